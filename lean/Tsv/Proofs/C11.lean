/-
C11 - the adjoint SDE's vector fields are the exact vector-Jacobian products (values, graph facts).

Every definition `Gen.adj_<call>_<i|s>_<noise>_<d><m>_<ng|en>_<output>` is regenerated on every run by running the REAL
`AdjointSDE` (on the real `ForwardSDE` of a user SDE whose drift and diffusion are uninterpreted function symbols of
(t, y, theta)) on symbolic tensors; `f_d1`, `g01_d13`, ... are the partial derivatives produced by the (symbolic) autograd
calls of the code.  Inputs: t = the adjoint's time argument (= MINUS the forward time), y_aug = (y, a, b, bu) = state, adjoint
of the state, running gradient of the used parameter `th`, of the unused parameter `thu`; v = the vector multiplying the
diffusion.  `ng` = traced under torch.no_grad(), `en` = under torch.enable_grad() with y_aug a leaf that requires grad.

  <prog>_spec               every component of the returned flat tensor = the Spec quantity (Spec/Adjoint.lean) of the jet of
                            (f, g) at time -t:   f -> stratDrift* / itoDrift*,  g_prod -> gProd*,  gdg -> gdg*
  <prog>_unused_param_zero  the block of the parameter the SDE does not use is exactly 0
  <prog>_pair               f_and_g_prod = (f, g_prod), g_prod_and_gdg_prod's first result = g_prod: component-wise equal to
                            the single calls
  <prog>_graph              graph discipline recorded while tracing: with grad disabled the results do not require grad and
                            have no grad_fn; with grad enabled they require grad; the caller's y_aug is left as it was
Derivatives of the enabled-mode outputs (`differentiable_when_enabled`): Tsv/Proofs/C11Jac.lean.
-/
import Tsv.Gen.Adjoint
import Tsv.Spec.Adjoint
import Mathlib.Algebra.CharZero.Defs

namespace C11
open Spec.Adjoint
set_option linter.unusedSectionVars false
set_option linter.unusedVariables false
set_option linter.unusedTactic false
set_option linter.unreachableTactic false
set_option linter.unusedSimpArgs false
variable {K : Type} [Field K] [LinearOrder K] [CharZero K]

/-- jet of the user SDE (diagonal noise, d = 1, m = 1) at (time -t, state y, used parameter th); the second parameter is not used: zero partials -/
def jet_diagonal_11 (f : K → K → K → K) (f_d1 : K → K → K → K) (f_d2 : K → K → K → K) (g : K → K → K → K) (g_d1 : K → K → K → K) (g_d11 : K → K → K → K) (g_d12 : K → K → K → K) (g_d2 : K → K → K → K) (t y0 th : K) : Jet K 1 1 2 where
  f := ![(f (-t) y0 th)]
  fy := ![![(f_d1 (-t) y0 th)]]
  fth := ![![(f_d2 (-t) y0 th), 0]]
  g := ![![(g (-t) y0 th)]]
  gy := ![![![(g_d1 (-t) y0 th)]]]
  gth := ![![![(g_d2 (-t) y0 th), 0]]]
  gyy := ![![![![(g_d11 (-t) y0 th)]]]]
  gyth := ![![![![(g_d12 (-t) y0 th), 0]]]]

/-- jet of the user SDE (diagonal noise, d = 2, m = 2) at (time -t, state y, used parameter th); the second parameter is not used: zero partials -/
def jet_diagonal_22 (f0 : K → K → K → K → K) (f0_d1 : K → K → K → K → K) (f0_d2 : K → K → K → K → K) (f0_d3 : K → K → K → K → K) (f1 : K → K → K → K → K) (f1_d1 : K → K → K → K → K) (f1_d2 : K → K → K → K → K) (f1_d3 : K → K → K → K → K) (g0 : K → K → K → K) (g0_d1 : K → K → K → K) (g0_d11 : K → K → K → K) (g0_d12 : K → K → K → K) (g0_d2 : K → K → K → K) (g1 : K → K → K → K) (g1_d1 : K → K → K → K) (g1_d11 : K → K → K → K) (g1_d12 : K → K → K → K) (g1_d2 : K → K → K → K) (t y0 y1 th : K) : Jet K 2 2 2 where
  f := ![(f0 (-t) y0 y1 th), (f1 (-t) y0 y1 th)]
  fy := ![![(f0_d1 (-t) y0 y1 th), (f0_d2 (-t) y0 y1 th)], ![(f1_d1 (-t) y0 y1 th), (f1_d2 (-t) y0 y1 th)]]
  fth := ![![(f0_d3 (-t) y0 y1 th), 0], ![(f1_d3 (-t) y0 y1 th), 0]]
  g := ![![(g0 (-t) y0 th), 0], ![0, (g1 (-t) y1 th)]]
  gy := ![![![(g0_d1 (-t) y0 th), 0], ![0, 0]], ![![0, 0], ![0, (g1_d1 (-t) y1 th)]]]
  gth := ![![![(g0_d2 (-t) y0 th), 0], ![0, 0]], ![![0, 0], ![(g1_d2 (-t) y1 th), 0]]]
  gyy := ![![![![(g0_d11 (-t) y0 th), 0], ![0, 0]], ![![0, 0], ![0, 0]]], ![![![0, 0], ![0, 0]], ![![0, 0], ![0, (g1_d11 (-t) y1 th)]]]]
  gyth := ![![![![(g0_d12 (-t) y0 th), 0], ![0, 0]], ![![0, 0], ![0, 0]]], ![![![0, 0], ![0, 0]], ![![0, 0], ![(g1_d12 (-t) y1 th), 0]]]]

/-- jet of the user SDE (additive noise, d = 1, m = 1) at (time -t, state y, used parameter th); the second parameter is not used: zero partials -/
def jet_additive_11 (f : K → K → K → K) (f_d1 : K → K → K → K) (f_d2 : K → K → K → K) (g : K → K → K) (g_d1 : K → K → K) (t y0 th : K) : Jet K 1 1 2 where
  f := ![(f (-t) y0 th)]
  fy := ![![(f_d1 (-t) y0 th)]]
  fth := ![![(f_d2 (-t) y0 th), 0]]
  g := ![![(g (-t) th)]]
  gy := ![![![0]]]
  gth := ![![![(g_d1 (-t) th), 0]]]
  gyy := ![![![![0]]]]
  gyth := ![![![![0, 0]]]]

/-- jet of the user SDE (scalar noise, d = 1, m = 1) at (time -t, state y, used parameter th); the second parameter is not used: zero partials -/
def jet_scalar_11 (f : K → K → K → K) (f_d1 : K → K → K → K) (f_d2 : K → K → K → K) (g : K → K → K → K) (g_d1 : K → K → K → K) (g_d11 : K → K → K → K) (g_d12 : K → K → K → K) (g_d2 : K → K → K → K) (t y0 th : K) : Jet K 1 1 2 where
  f := ![(f (-t) y0 th)]
  fy := ![![(f_d1 (-t) y0 th)]]
  fth := ![![(f_d2 (-t) y0 th), 0]]
  g := ![![(g (-t) y0 th)]]
  gy := ![![![(g_d1 (-t) y0 th)]]]
  gth := ![![![(g_d2 (-t) y0 th), 0]]]
  gyy := ![![![![(g_d11 (-t) y0 th)]]]]
  gyth := ![![![![(g_d12 (-t) y0 th), 0]]]]

/-- jet of the user SDE (scalar noise, d = 2, m = 1) at (time -t, state y, used parameter th); the second parameter is not used: zero partials -/
def jet_scalar_21 (f0 : K → K → K → K → K) (f0_d1 : K → K → K → K → K) (f0_d2 : K → K → K → K → K) (f0_d3 : K → K → K → K → K) (f1 : K → K → K → K → K) (f1_d1 : K → K → K → K → K) (f1_d2 : K → K → K → K → K) (f1_d3 : K → K → K → K → K) (g00 : K → K → K → K → K) (g00_d1 : K → K → K → K → K) (g00_d11 : K → K → K → K → K) (g00_d12 : K → K → K → K → K) (g00_d13 : K → K → K → K → K) (g00_d2 : K → K → K → K → K) (g00_d22 : K → K → K → K → K) (g00_d23 : K → K → K → K → K) (g00_d3 : K → K → K → K → K) (g10 : K → K → K → K → K) (g10_d1 : K → K → K → K → K) (g10_d11 : K → K → K → K → K) (g10_d12 : K → K → K → K → K) (g10_d13 : K → K → K → K → K) (g10_d2 : K → K → K → K → K) (g10_d22 : K → K → K → K → K) (g10_d23 : K → K → K → K → K) (g10_d3 : K → K → K → K → K) (t y0 y1 th : K) : Jet K 2 1 2 where
  f := ![(f0 (-t) y0 y1 th), (f1 (-t) y0 y1 th)]
  fy := ![![(f0_d1 (-t) y0 y1 th), (f0_d2 (-t) y0 y1 th)], ![(f1_d1 (-t) y0 y1 th), (f1_d2 (-t) y0 y1 th)]]
  fth := ![![(f0_d3 (-t) y0 y1 th), 0], ![(f1_d3 (-t) y0 y1 th), 0]]
  g := ![![(g00 (-t) y0 y1 th)], ![(g10 (-t) y0 y1 th)]]
  gy := ![![![(g00_d1 (-t) y0 y1 th), (g00_d2 (-t) y0 y1 th)]], ![![(g10_d1 (-t) y0 y1 th), (g10_d2 (-t) y0 y1 th)]]]
  gth := ![![![(g00_d3 (-t) y0 y1 th), 0]], ![![(g10_d3 (-t) y0 y1 th), 0]]]
  gyy := ![![![![(g00_d11 (-t) y0 y1 th), (g00_d12 (-t) y0 y1 th)], ![(g00_d12 (-t) y0 y1 th), (g00_d22 (-t) y0 y1 th)]]], ![![![(g10_d11 (-t) y0 y1 th), (g10_d12 (-t) y0 y1 th)], ![(g10_d12 (-t) y0 y1 th), (g10_d22 (-t) y0 y1 th)]]]]
  gyth := ![![![![(g00_d13 (-t) y0 y1 th), 0], ![(g00_d23 (-t) y0 y1 th), 0]]], ![![![(g10_d13 (-t) y0 y1 th), 0], ![(g10_d23 (-t) y0 y1 th), 0]]]]

/-- jet of the user SDE (general noise, d = 1, m = 1) at (time -t, state y, used parameter th); the second parameter is not used: zero partials -/
def jet_general_11 (f : K → K → K → K) (f_d1 : K → K → K → K) (f_d2 : K → K → K → K) (g : K → K → K → K) (g_d1 : K → K → K → K) (g_d11 : K → K → K → K) (g_d12 : K → K → K → K) (g_d2 : K → K → K → K) (t y0 th : K) : Jet K 1 1 2 where
  f := ![(f (-t) y0 th)]
  fy := ![![(f_d1 (-t) y0 th)]]
  fth := ![![(f_d2 (-t) y0 th), 0]]
  g := ![![(g (-t) y0 th)]]
  gy := ![![![(g_d1 (-t) y0 th)]]]
  gth := ![![![(g_d2 (-t) y0 th), 0]]]
  gyy := ![![![![(g_d11 (-t) y0 th)]]]]
  gyth := ![![![![(g_d12 (-t) y0 th), 0]]]]

/-- jet of the user SDE (general noise, d = 2, m = 2) at (time -t, state y, used parameter th); the second parameter is not used: zero partials -/
def jet_general_22 (f0 : K → K → K → K → K) (f0_d1 : K → K → K → K → K) (f0_d2 : K → K → K → K → K) (f0_d3 : K → K → K → K → K) (f1 : K → K → K → K → K) (f1_d1 : K → K → K → K → K) (f1_d2 : K → K → K → K → K) (f1_d3 : K → K → K → K → K) (g00 : K → K → K → K → K) (g00_d1 : K → K → K → K → K) (g00_d11 : K → K → K → K → K) (g00_d12 : K → K → K → K → K) (g00_d13 : K → K → K → K → K) (g00_d2 : K → K → K → K → K) (g00_d22 : K → K → K → K → K) (g00_d23 : K → K → K → K → K) (g00_d3 : K → K → K → K → K) (g01 : K → K → K → K → K) (g01_d1 : K → K → K → K → K) (g01_d11 : K → K → K → K → K) (g01_d12 : K → K → K → K → K) (g01_d13 : K → K → K → K → K) (g01_d2 : K → K → K → K → K) (g01_d22 : K → K → K → K → K) (g01_d23 : K → K → K → K → K) (g01_d3 : K → K → K → K → K) (g10 : K → K → K → K → K) (g10_d1 : K → K → K → K → K) (g10_d11 : K → K → K → K → K) (g10_d12 : K → K → K → K → K) (g10_d13 : K → K → K → K → K) (g10_d2 : K → K → K → K → K) (g10_d22 : K → K → K → K → K) (g10_d23 : K → K → K → K → K) (g10_d3 : K → K → K → K → K) (g11 : K → K → K → K → K) (g11_d1 : K → K → K → K → K) (g11_d11 : K → K → K → K → K) (g11_d12 : K → K → K → K → K) (g11_d13 : K → K → K → K → K) (g11_d2 : K → K → K → K → K) (g11_d22 : K → K → K → K → K) (g11_d23 : K → K → K → K → K) (g11_d3 : K → K → K → K → K) (t y0 y1 th : K) : Jet K 2 2 2 where
  f := ![(f0 (-t) y0 y1 th), (f1 (-t) y0 y1 th)]
  fy := ![![(f0_d1 (-t) y0 y1 th), (f0_d2 (-t) y0 y1 th)], ![(f1_d1 (-t) y0 y1 th), (f1_d2 (-t) y0 y1 th)]]
  fth := ![![(f0_d3 (-t) y0 y1 th), 0], ![(f1_d3 (-t) y0 y1 th), 0]]
  g := ![![(g00 (-t) y0 y1 th), (g01 (-t) y0 y1 th)], ![(g10 (-t) y0 y1 th), (g11 (-t) y0 y1 th)]]
  gy := ![![![(g00_d1 (-t) y0 y1 th), (g00_d2 (-t) y0 y1 th)], ![(g01_d1 (-t) y0 y1 th), (g01_d2 (-t) y0 y1 th)]], ![![(g10_d1 (-t) y0 y1 th), (g10_d2 (-t) y0 y1 th)], ![(g11_d1 (-t) y0 y1 th), (g11_d2 (-t) y0 y1 th)]]]
  gth := ![![![(g00_d3 (-t) y0 y1 th), 0], ![(g01_d3 (-t) y0 y1 th), 0]], ![![(g10_d3 (-t) y0 y1 th), 0], ![(g11_d3 (-t) y0 y1 th), 0]]]
  gyy := ![![![![(g00_d11 (-t) y0 y1 th), (g00_d12 (-t) y0 y1 th)], ![(g00_d12 (-t) y0 y1 th), (g00_d22 (-t) y0 y1 th)]], ![![(g01_d11 (-t) y0 y1 th), (g01_d12 (-t) y0 y1 th)], ![(g01_d12 (-t) y0 y1 th), (g01_d22 (-t) y0 y1 th)]]], ![![![(g10_d11 (-t) y0 y1 th), (g10_d12 (-t) y0 y1 th)], ![(g10_d12 (-t) y0 y1 th), (g10_d22 (-t) y0 y1 th)]], ![![(g11_d11 (-t) y0 y1 th), (g11_d12 (-t) y0 y1 th)], ![(g11_d12 (-t) y0 y1 th), (g11_d22 (-t) y0 y1 th)]]]]
  gyth := ![![![![(g00_d13 (-t) y0 y1 th), 0], ![(g00_d23 (-t) y0 y1 th), 0]], ![![(g01_d13 (-t) y0 y1 th), 0], ![(g01_d23 (-t) y0 y1 th), 0]]], ![![![(g10_d13 (-t) y0 y1 th), 0], ![(g10_d23 (-t) y0 y1 th), 0]], ![![(g11_d13 (-t) y0 y1 th), 0], ![(g11_d23 (-t) y0 y1 th), 0]]]]

theorem adj_f_i_diagonal_11_ng_spec (f : K → K → K → K) (f_d1 : K → K → K → K) (f_d2 : K → K → K → K) (g : K → K → K → K) (g_d1 : K → K → K → K) (g_d11 : K → K → K → K) (g_d12 : K → K → K → K) (g_d2 : K → K → K → K) (t y0 a0 b bu th thu : K) :
    Gen.adj_f_i_diagonal_11_ng_out_0_0 f f_d1 f_d2 g g_d1 g_d11 g_d12 g_d2 t y0 a0 b bu th thu
      = itoDriftY (jet_diagonal_11 f f_d1 f_d2 g g_d1 g_d11 g_d12 g_d2 t y0 th) 0 ∧
    Gen.adj_f_i_diagonal_11_ng_out_0_1 f f_d1 f_d2 g g_d1 g_d11 g_d12 g_d2 t y0 a0 b bu th thu
      = itoDriftA (jet_diagonal_11 f f_d1 f_d2 g g_d1 g_d11 g_d12 g_d2 t y0 th) ![a0] 0 ∧
    Gen.adj_f_i_diagonal_11_ng_out_0_2 f f_d1 f_d2 g g_d1 g_d11 g_d12 g_d2 t y0 a0 b bu th thu
      = itoDriftTh (jet_diagonal_11 f f_d1 f_d2 g g_d1 g_d11 g_d12 g_d2 t y0 th) ![a0] 0 ∧
    Gen.adj_f_i_diagonal_11_ng_out_0_3 f f_d1 f_d2 g g_d1 g_d11 g_d12 g_d2 t y0 a0 b bu th thu
      = itoDriftTh (jet_diagonal_11 f f_d1 f_d2 g g_d1 g_d11 g_d12 g_d2 t y0 th) ![a0] 1 := by
  refine ⟨?_, ?_, ?_, ?_⟩ <;>
  simp [Gen.adj_f_i_diagonal_11_ng_out_0_0, Gen.adj_f_i_diagonal_11_ng_out_0_1, Gen.adj_f_i_diagonal_11_ng_out_0_2, Gen.adj_f_i_diagonal_11_ng_out_0_3, jet_diagonal_11, stratDriftY, stratDriftA, stratDriftTh, itoDriftY, itoDriftA, itoDriftTh, gProdY, gProdA, gProdTh, gdgY, gdgA, gdgTh, driftY, driftA, driftTh, diffY, diffA, diffTh, itoCorr, itoCorrY, itoCorrTh, fStrat, fStratY, fStratTh, colCorrY, colCorrA, colCorrTh, Fin.sum_univ_two, Fin.sum_univ_one, Fin.isValue, Matrix.cons_val_zero, Matrix.cons_val_one, Matrix.cons_val_fin_one, Matrix.head_cons] <;> ring

theorem adj_f_i_diagonal_11_ng_unused_param_zero (f : K → K → K → K) (f_d1 : K → K → K → K) (f_d2 : K → K → K → K) (g : K → K → K → K) (g_d1 : K → K → K → K) (g_d11 : K → K → K → K) (g_d12 : K → K → K → K) (g_d2 : K → K → K → K) (t y0 a0 b bu th thu : K) :
    Gen.adj_f_i_diagonal_11_ng_out_0_3 f f_d1 f_d2 g g_d1 g_d11 g_d12 g_d2 t y0 a0 b bu th thu = 0 := by
  simp [Gen.adj_f_i_diagonal_11_ng_out_0_3]

theorem adj_f_i_diagonal_11_ng_graph (f : K → K → K → K) (f_d1 : K → K → K → K) (f_d2 : K → K → K → K) (g : K → K → K → K) (g_d1 : K → K → K → K) (g_d11 : K → K → K → K) (g_d12 : K → K → K → K) (g_d2 : K → K → K → K) (t y0 a0 b bu th thu : K) :
    Gen.adj_f_i_diagonal_11_ng_rg_out f f_d1 f_d2 g g_d1 g_d11 g_d12 g_d2 t y0 a0 b bu th thu = 0 ∧
    Gen.adj_f_i_diagonal_11_ng_leaf_out f f_d1 f_d2 g g_d1 g_d11 g_d12 g_d2 t y0 a0 b bu th thu = 1 ∧
    Gen.adj_f_i_diagonal_11_ng_rg_z_after f f_d1 f_d2 g g_d1 g_d11 g_d12 g_d2 t y0 a0 b bu th thu = 0 ∧
    Gen.adj_f_i_diagonal_11_ng_leaf_z_after f f_d1 f_d2 g g_d1 g_d11 g_d12 g_d2 t y0 a0 b bu th thu = 1 := by
  refine ⟨?_, ?_, ?_, ?_⟩ <;> simp only [Gen.adj_f_i_diagonal_11_ng_rg_out, Gen.adj_f_i_diagonal_11_ng_leaf_out, Gen.adj_f_i_diagonal_11_ng_rg_z_after, Gen.adj_f_i_diagonal_11_ng_leaf_z_after]

theorem adj_f_i_diagonal_11_en_spec (f : K → K → K → K) (f_d1 : K → K → K → K) (f_d11 : K → K → K → K) (f_d12 : K → K → K → K) (f_d2 : K → K → K → K) (f_d22 : K → K → K → K) (g : K → K → K → K) (g_d1 : K → K → K → K) (g_d11 : K → K → K → K) (g_d111 : K → K → K → K) (g_d112 : K → K → K → K) (g_d12 : K → K → K → K) (g_d122 : K → K → K → K) (g_d2 : K → K → K → K) (g_d22 : K → K → K → K) (t y0 a0 b bu th thu : K) :
    Gen.adj_f_i_diagonal_11_en_out_0_0 f f_d1 f_d11 f_d12 f_d2 f_d22 g g_d1 g_d11 g_d111 g_d112 g_d12 g_d122 g_d2 g_d22 t y0 a0 b bu th thu
      = itoDriftY (jet_diagonal_11 f f_d1 f_d2 g g_d1 g_d11 g_d12 g_d2 t y0 th) 0 ∧
    Gen.adj_f_i_diagonal_11_en_out_0_1 f f_d1 f_d11 f_d12 f_d2 f_d22 g g_d1 g_d11 g_d111 g_d112 g_d12 g_d122 g_d2 g_d22 t y0 a0 b bu th thu
      = itoDriftA (jet_diagonal_11 f f_d1 f_d2 g g_d1 g_d11 g_d12 g_d2 t y0 th) ![a0] 0 ∧
    Gen.adj_f_i_diagonal_11_en_out_0_2 f f_d1 f_d11 f_d12 f_d2 f_d22 g g_d1 g_d11 g_d111 g_d112 g_d12 g_d122 g_d2 g_d22 t y0 a0 b bu th thu
      = itoDriftTh (jet_diagonal_11 f f_d1 f_d2 g g_d1 g_d11 g_d12 g_d2 t y0 th) ![a0] 0 ∧
    Gen.adj_f_i_diagonal_11_en_out_0_3 f f_d1 f_d11 f_d12 f_d2 f_d22 g g_d1 g_d11 g_d111 g_d112 g_d12 g_d122 g_d2 g_d22 t y0 a0 b bu th thu
      = itoDriftTh (jet_diagonal_11 f f_d1 f_d2 g g_d1 g_d11 g_d12 g_d2 t y0 th) ![a0] 1 := by
  refine ⟨?_, ?_, ?_, ?_⟩ <;>
  simp [Gen.adj_f_i_diagonal_11_en_out_0_0, Gen.adj_f_i_diagonal_11_en_out_0_1, Gen.adj_f_i_diagonal_11_en_out_0_2, Gen.adj_f_i_diagonal_11_en_out_0_3, jet_diagonal_11, stratDriftY, stratDriftA, stratDriftTh, itoDriftY, itoDriftA, itoDriftTh, gProdY, gProdA, gProdTh, gdgY, gdgA, gdgTh, driftY, driftA, driftTh, diffY, diffA, diffTh, itoCorr, itoCorrY, itoCorrTh, fStrat, fStratY, fStratTh, colCorrY, colCorrA, colCorrTh, Fin.sum_univ_two, Fin.sum_univ_one, Fin.isValue, Matrix.cons_val_zero, Matrix.cons_val_one, Matrix.cons_val_fin_one, Matrix.head_cons] <;> ring

theorem adj_f_i_diagonal_11_en_unused_param_zero (f : K → K → K → K) (f_d1 : K → K → K → K) (f_d11 : K → K → K → K) (f_d12 : K → K → K → K) (f_d2 : K → K → K → K) (f_d22 : K → K → K → K) (g : K → K → K → K) (g_d1 : K → K → K → K) (g_d11 : K → K → K → K) (g_d111 : K → K → K → K) (g_d112 : K → K → K → K) (g_d12 : K → K → K → K) (g_d122 : K → K → K → K) (g_d2 : K → K → K → K) (g_d22 : K → K → K → K) (t y0 a0 b bu th thu : K) :
    Gen.adj_f_i_diagonal_11_en_out_0_3 f f_d1 f_d11 f_d12 f_d2 f_d22 g g_d1 g_d11 g_d111 g_d112 g_d12 g_d122 g_d2 g_d22 t y0 a0 b bu th thu = 0 := by
  simp [Gen.adj_f_i_diagonal_11_en_out_0_3]

theorem adj_f_i_diagonal_11_en_graph (f : K → K → K → K) (f_d1 : K → K → K → K) (f_d11 : K → K → K → K) (f_d12 : K → K → K → K) (f_d2 : K → K → K → K) (f_d22 : K → K → K → K) (g : K → K → K → K) (g_d1 : K → K → K → K) (g_d11 : K → K → K → K) (g_d111 : K → K → K → K) (g_d112 : K → K → K → K) (g_d12 : K → K → K → K) (g_d122 : K → K → K → K) (g_d2 : K → K → K → K) (g_d22 : K → K → K → K) (t y0 a0 b bu th thu : K) :
    Gen.adj_f_i_diagonal_11_en_rg_out f f_d1 f_d11 f_d12 f_d2 f_d22 g g_d1 g_d11 g_d111 g_d112 g_d12 g_d122 g_d2 g_d22 t y0 a0 b bu th thu = 1 ∧
    Gen.adj_f_i_diagonal_11_en_leaf_out f f_d1 f_d11 f_d12 f_d2 f_d22 g g_d1 g_d11 g_d111 g_d112 g_d12 g_d122 g_d2 g_d22 t y0 a0 b bu th thu = 0 ∧
    Gen.adj_f_i_diagonal_11_en_rg_z_after f f_d1 f_d11 f_d12 f_d2 f_d22 g g_d1 g_d11 g_d111 g_d112 g_d12 g_d122 g_d2 g_d22 t y0 a0 b bu th thu = 1 ∧
    Gen.adj_f_i_diagonal_11_en_leaf_z_after f f_d1 f_d11 f_d12 f_d2 f_d22 g g_d1 g_d11 g_d111 g_d112 g_d12 g_d122 g_d2 g_d22 t y0 a0 b bu th thu = 1 := by
  refine ⟨?_, ?_, ?_, ?_⟩ <;> simp only [Gen.adj_f_i_diagonal_11_en_rg_out, Gen.adj_f_i_diagonal_11_en_leaf_out, Gen.adj_f_i_diagonal_11_en_rg_z_after, Gen.adj_f_i_diagonal_11_en_leaf_z_after]

theorem adj_gp_i_diagonal_11_ng_spec (f : K → K → K → K) (f_d1 : K → K → K → K) (f_d2 : K → K → K → K) (g : K → K → K → K) (g_d1 : K → K → K → K) (g_d11 : K → K → K → K) (g_d12 : K → K → K → K) (g_d2 : K → K → K → K) (t y0 a0 b bu th thu v0 : K) :
    Gen.adj_gp_i_diagonal_11_ng_out_0_0 g g_d1 g_d2 t y0 a0 b bu th thu v0
      = gProdY (jet_diagonal_11 f f_d1 f_d2 g g_d1 g_d11 g_d12 g_d2 t y0 th) ![v0] 0 ∧
    Gen.adj_gp_i_diagonal_11_ng_out_0_1 g g_d1 g_d2 t y0 a0 b bu th thu v0
      = gProdA (jet_diagonal_11 f f_d1 f_d2 g g_d1 g_d11 g_d12 g_d2 t y0 th) ![a0] ![v0] 0 ∧
    Gen.adj_gp_i_diagonal_11_ng_out_0_2 g g_d1 g_d2 t y0 a0 b bu th thu v0
      = gProdTh (jet_diagonal_11 f f_d1 f_d2 g g_d1 g_d11 g_d12 g_d2 t y0 th) ![a0] ![v0] 0 ∧
    Gen.adj_gp_i_diagonal_11_ng_out_0_3 g g_d1 g_d2 t y0 a0 b bu th thu v0
      = gProdTh (jet_diagonal_11 f f_d1 f_d2 g g_d1 g_d11 g_d12 g_d2 t y0 th) ![a0] ![v0] 1 := by
  refine ⟨?_, ?_, ?_, ?_⟩ <;>
  simp [Gen.adj_gp_i_diagonal_11_ng_out_0_0, Gen.adj_gp_i_diagonal_11_ng_out_0_1, Gen.adj_gp_i_diagonal_11_ng_out_0_2, Gen.adj_gp_i_diagonal_11_ng_out_0_3, jet_diagonal_11, stratDriftY, stratDriftA, stratDriftTh, itoDriftY, itoDriftA, itoDriftTh, gProdY, gProdA, gProdTh, gdgY, gdgA, gdgTh, driftY, driftA, driftTh, diffY, diffA, diffTh, itoCorr, itoCorrY, itoCorrTh, fStrat, fStratY, fStratTh, colCorrY, colCorrA, colCorrTh, Fin.sum_univ_two, Fin.sum_univ_one, Fin.isValue, Matrix.cons_val_zero, Matrix.cons_val_one, Matrix.cons_val_fin_one, Matrix.head_cons] <;> ring

theorem adj_gp_i_diagonal_11_ng_unused_param_zero (f : K → K → K → K) (f_d1 : K → K → K → K) (f_d2 : K → K → K → K) (g : K → K → K → K) (g_d1 : K → K → K → K) (g_d11 : K → K → K → K) (g_d12 : K → K → K → K) (g_d2 : K → K → K → K) (t y0 a0 b bu th thu v0 : K) :
    Gen.adj_gp_i_diagonal_11_ng_out_0_3 g g_d1 g_d2 t y0 a0 b bu th thu v0 = 0 := by
  simp [Gen.adj_gp_i_diagonal_11_ng_out_0_3]

theorem adj_gp_i_diagonal_11_ng_graph (f : K → K → K → K) (f_d1 : K → K → K → K) (f_d2 : K → K → K → K) (g : K → K → K → K) (g_d1 : K → K → K → K) (g_d11 : K → K → K → K) (g_d12 : K → K → K → K) (g_d2 : K → K → K → K) (t y0 a0 b bu th thu v0 : K) :
    Gen.adj_gp_i_diagonal_11_ng_rg_out g g_d1 g_d2 t y0 a0 b bu th thu v0 = 0 ∧
    Gen.adj_gp_i_diagonal_11_ng_leaf_out g g_d1 g_d2 t y0 a0 b bu th thu v0 = 1 ∧
    Gen.adj_gp_i_diagonal_11_ng_rg_z_after g g_d1 g_d2 t y0 a0 b bu th thu v0 = 0 ∧
    Gen.adj_gp_i_diagonal_11_ng_leaf_z_after g g_d1 g_d2 t y0 a0 b bu th thu v0 = 1 := by
  refine ⟨?_, ?_, ?_, ?_⟩ <;> simp only [Gen.adj_gp_i_diagonal_11_ng_rg_out, Gen.adj_gp_i_diagonal_11_ng_leaf_out, Gen.adj_gp_i_diagonal_11_ng_rg_z_after, Gen.adj_gp_i_diagonal_11_ng_leaf_z_after]

theorem adj_gp_i_diagonal_11_en_spec (f : K → K → K → K) (f_d1 : K → K → K → K) (f_d2 : K → K → K → K) (g : K → K → K → K) (g_d1 : K → K → K → K) (g_d11 : K → K → K → K) (g_d12 : K → K → K → K) (g_d2 : K → K → K → K) (g_d22 : K → K → K → K) (t y0 a0 b bu th thu v0 : K) :
    Gen.adj_gp_i_diagonal_11_en_out_0_0 g g_d1 g_d11 g_d12 g_d2 g_d22 t y0 a0 b bu th thu v0
      = gProdY (jet_diagonal_11 f f_d1 f_d2 g g_d1 g_d11 g_d12 g_d2 t y0 th) ![v0] 0 ∧
    Gen.adj_gp_i_diagonal_11_en_out_0_1 g g_d1 g_d11 g_d12 g_d2 g_d22 t y0 a0 b bu th thu v0
      = gProdA (jet_diagonal_11 f f_d1 f_d2 g g_d1 g_d11 g_d12 g_d2 t y0 th) ![a0] ![v0] 0 ∧
    Gen.adj_gp_i_diagonal_11_en_out_0_2 g g_d1 g_d11 g_d12 g_d2 g_d22 t y0 a0 b bu th thu v0
      = gProdTh (jet_diagonal_11 f f_d1 f_d2 g g_d1 g_d11 g_d12 g_d2 t y0 th) ![a0] ![v0] 0 ∧
    Gen.adj_gp_i_diagonal_11_en_out_0_3 g g_d1 g_d11 g_d12 g_d2 g_d22 t y0 a0 b bu th thu v0
      = gProdTh (jet_diagonal_11 f f_d1 f_d2 g g_d1 g_d11 g_d12 g_d2 t y0 th) ![a0] ![v0] 1 := by
  refine ⟨?_, ?_, ?_, ?_⟩ <;>
  simp [Gen.adj_gp_i_diagonal_11_en_out_0_0, Gen.adj_gp_i_diagonal_11_en_out_0_1, Gen.adj_gp_i_diagonal_11_en_out_0_2, Gen.adj_gp_i_diagonal_11_en_out_0_3, jet_diagonal_11, stratDriftY, stratDriftA, stratDriftTh, itoDriftY, itoDriftA, itoDriftTh, gProdY, gProdA, gProdTh, gdgY, gdgA, gdgTh, driftY, driftA, driftTh, diffY, diffA, diffTh, itoCorr, itoCorrY, itoCorrTh, fStrat, fStratY, fStratTh, colCorrY, colCorrA, colCorrTh, Fin.sum_univ_two, Fin.sum_univ_one, Fin.isValue, Matrix.cons_val_zero, Matrix.cons_val_one, Matrix.cons_val_fin_one, Matrix.head_cons] <;> ring

theorem adj_gp_i_diagonal_11_en_unused_param_zero (f : K → K → K → K) (f_d1 : K → K → K → K) (f_d2 : K → K → K → K) (g : K → K → K → K) (g_d1 : K → K → K → K) (g_d11 : K → K → K → K) (g_d12 : K → K → K → K) (g_d2 : K → K → K → K) (g_d22 : K → K → K → K) (t y0 a0 b bu th thu v0 : K) :
    Gen.adj_gp_i_diagonal_11_en_out_0_3 g g_d1 g_d11 g_d12 g_d2 g_d22 t y0 a0 b bu th thu v0 = 0 := by
  simp [Gen.adj_gp_i_diagonal_11_en_out_0_3]

theorem adj_gp_i_diagonal_11_en_graph (f : K → K → K → K) (f_d1 : K → K → K → K) (f_d2 : K → K → K → K) (g : K → K → K → K) (g_d1 : K → K → K → K) (g_d11 : K → K → K → K) (g_d12 : K → K → K → K) (g_d2 : K → K → K → K) (g_d22 : K → K → K → K) (t y0 a0 b bu th thu v0 : K) :
    Gen.adj_gp_i_diagonal_11_en_rg_out g g_d1 g_d11 g_d12 g_d2 g_d22 t y0 a0 b bu th thu v0 = 1 ∧
    Gen.adj_gp_i_diagonal_11_en_leaf_out g g_d1 g_d11 g_d12 g_d2 g_d22 t y0 a0 b bu th thu v0 = 0 ∧
    Gen.adj_gp_i_diagonal_11_en_rg_z_after g g_d1 g_d11 g_d12 g_d2 g_d22 t y0 a0 b bu th thu v0 = 1 ∧
    Gen.adj_gp_i_diagonal_11_en_leaf_z_after g g_d1 g_d11 g_d12 g_d2 g_d22 t y0 a0 b bu th thu v0 = 1 := by
  refine ⟨?_, ?_, ?_, ?_⟩ <;> simp only [Gen.adj_gp_i_diagonal_11_en_rg_out, Gen.adj_gp_i_diagonal_11_en_leaf_out, Gen.adj_gp_i_diagonal_11_en_rg_z_after, Gen.adj_gp_i_diagonal_11_en_leaf_z_after]

theorem adj_fgp_i_diagonal_11_ng_unused_param_zero (f : K → K → K → K) (f_d1 : K → K → K → K) (f_d2 : K → K → K → K) (g : K → K → K → K) (g_d1 : K → K → K → K) (g_d11 : K → K → K → K) (g_d12 : K → K → K → K) (g_d2 : K → K → K → K) (t y0 a0 b bu th thu v0 : K) :
    Gen.adj_fgp_i_diagonal_11_ng_f_0_3 f f_d1 f_d2 g g_d1 g_d11 g_d12 g_d2 t y0 a0 b bu th thu v0 = 0 ∧
    Gen.adj_fgp_i_diagonal_11_ng_gp_0_3 f f_d1 f_d2 g g_d1 g_d11 g_d12 g_d2 t y0 a0 b bu th thu v0 = 0 := by
  refine ⟨?_, ?_⟩ <;> simp [Gen.adj_fgp_i_diagonal_11_ng_f_0_3, Gen.adj_fgp_i_diagonal_11_ng_gp_0_3]

theorem adj_fgp_i_diagonal_11_ng_pair (f : K → K → K → K) (f_d1 : K → K → K → K) (f_d2 : K → K → K → K) (g : K → K → K → K) (g_d1 : K → K → K → K) (g_d11 : K → K → K → K) (g_d12 : K → K → K → K) (g_d2 : K → K → K → K) (t y0 a0 b bu th thu v0 : K) :
    Gen.adj_fgp_i_diagonal_11_ng_f_0_0 f f_d1 f_d2 g g_d1 g_d11 g_d12 g_d2 t y0 a0 b bu th thu v0
      = Gen.adj_f_i_diagonal_11_ng_out_0_0 f f_d1 f_d2 g g_d1 g_d11 g_d12 g_d2 t y0 a0 b bu th thu ∧
    Gen.adj_fgp_i_diagonal_11_ng_f_0_1 f f_d1 f_d2 g g_d1 g_d11 g_d12 g_d2 t y0 a0 b bu th thu v0
      = Gen.adj_f_i_diagonal_11_ng_out_0_1 f f_d1 f_d2 g g_d1 g_d11 g_d12 g_d2 t y0 a0 b bu th thu ∧
    Gen.adj_fgp_i_diagonal_11_ng_f_0_2 f f_d1 f_d2 g g_d1 g_d11 g_d12 g_d2 t y0 a0 b bu th thu v0
      = Gen.adj_f_i_diagonal_11_ng_out_0_2 f f_d1 f_d2 g g_d1 g_d11 g_d12 g_d2 t y0 a0 b bu th thu ∧
    Gen.adj_fgp_i_diagonal_11_ng_f_0_3 f f_d1 f_d2 g g_d1 g_d11 g_d12 g_d2 t y0 a0 b bu th thu v0
      = Gen.adj_f_i_diagonal_11_ng_out_0_3 f f_d1 f_d2 g g_d1 g_d11 g_d12 g_d2 t y0 a0 b bu th thu ∧
    Gen.adj_fgp_i_diagonal_11_ng_gp_0_0 f f_d1 f_d2 g g_d1 g_d11 g_d12 g_d2 t y0 a0 b bu th thu v0
      = Gen.adj_gp_i_diagonal_11_ng_out_0_0 g g_d1 g_d2 t y0 a0 b bu th thu v0 ∧
    Gen.adj_fgp_i_diagonal_11_ng_gp_0_1 f f_d1 f_d2 g g_d1 g_d11 g_d12 g_d2 t y0 a0 b bu th thu v0
      = Gen.adj_gp_i_diagonal_11_ng_out_0_1 g g_d1 g_d2 t y0 a0 b bu th thu v0 ∧
    Gen.adj_fgp_i_diagonal_11_ng_gp_0_2 f f_d1 f_d2 g g_d1 g_d11 g_d12 g_d2 t y0 a0 b bu th thu v0
      = Gen.adj_gp_i_diagonal_11_ng_out_0_2 g g_d1 g_d2 t y0 a0 b bu th thu v0 ∧
    Gen.adj_fgp_i_diagonal_11_ng_gp_0_3 f f_d1 f_d2 g g_d1 g_d11 g_d12 g_d2 t y0 a0 b bu th thu v0
      = Gen.adj_gp_i_diagonal_11_ng_out_0_3 g g_d1 g_d2 t y0 a0 b bu th thu v0 := by
  refine ⟨?_, ?_, ?_, ?_, ?_, ?_, ?_, ?_⟩ <;> simp only [Gen.adj_fgp_i_diagonal_11_ng_f_0_0, Gen.adj_f_i_diagonal_11_ng_out_0_0, Gen.adj_fgp_i_diagonal_11_ng_f_0_1, Gen.adj_f_i_diagonal_11_ng_out_0_1, Gen.adj_fgp_i_diagonal_11_ng_f_0_2, Gen.adj_f_i_diagonal_11_ng_out_0_2, Gen.adj_fgp_i_diagonal_11_ng_f_0_3, Gen.adj_f_i_diagonal_11_ng_out_0_3, Gen.adj_fgp_i_diagonal_11_ng_gp_0_0, Gen.adj_gp_i_diagonal_11_ng_out_0_0, Gen.adj_fgp_i_diagonal_11_ng_gp_0_1, Gen.adj_gp_i_diagonal_11_ng_out_0_1, Gen.adj_fgp_i_diagonal_11_ng_gp_0_2, Gen.adj_gp_i_diagonal_11_ng_out_0_2, Gen.adj_fgp_i_diagonal_11_ng_gp_0_3, Gen.adj_gp_i_diagonal_11_ng_out_0_3] <;> ring

theorem adj_fgp_i_diagonal_11_ng_graph (f : K → K → K → K) (f_d1 : K → K → K → K) (f_d2 : K → K → K → K) (g : K → K → K → K) (g_d1 : K → K → K → K) (g_d11 : K → K → K → K) (g_d12 : K → K → K → K) (g_d2 : K → K → K → K) (t y0 a0 b bu th thu v0 : K) :
    Gen.adj_fgp_i_diagonal_11_ng_rg_f f f_d1 f_d2 g g_d1 g_d11 g_d12 g_d2 t y0 a0 b bu th thu v0 = 0 ∧
    Gen.adj_fgp_i_diagonal_11_ng_leaf_f f f_d1 f_d2 g g_d1 g_d11 g_d12 g_d2 t y0 a0 b bu th thu v0 = 1 ∧
    Gen.adj_fgp_i_diagonal_11_ng_rg_gp f f_d1 f_d2 g g_d1 g_d11 g_d12 g_d2 t y0 a0 b bu th thu v0 = 0 ∧
    Gen.adj_fgp_i_diagonal_11_ng_leaf_gp f f_d1 f_d2 g g_d1 g_d11 g_d12 g_d2 t y0 a0 b bu th thu v0 = 1 ∧
    Gen.adj_fgp_i_diagonal_11_ng_rg_z_after f f_d1 f_d2 g g_d1 g_d11 g_d12 g_d2 t y0 a0 b bu th thu v0 = 0 ∧
    Gen.adj_fgp_i_diagonal_11_ng_leaf_z_after f f_d1 f_d2 g g_d1 g_d11 g_d12 g_d2 t y0 a0 b bu th thu v0 = 1 := by
  refine ⟨?_, ?_, ?_, ?_, ?_, ?_⟩ <;> simp only [Gen.adj_fgp_i_diagonal_11_ng_rg_f, Gen.adj_fgp_i_diagonal_11_ng_leaf_f, Gen.adj_fgp_i_diagonal_11_ng_rg_gp, Gen.adj_fgp_i_diagonal_11_ng_leaf_gp, Gen.adj_fgp_i_diagonal_11_ng_rg_z_after, Gen.adj_fgp_i_diagonal_11_ng_leaf_z_after]

theorem adj_fgp_i_diagonal_11_en_unused_param_zero (f : K → K → K → K) (f_d1 : K → K → K → K) (f_d2 : K → K → K → K) (g : K → K → K → K) (g_d1 : K → K → K → K) (g_d11 : K → K → K → K) (g_d12 : K → K → K → K) (g_d2 : K → K → K → K) (t y0 a0 b bu th thu v0 : K) :
    Gen.adj_fgp_i_diagonal_11_en_f_0_3 f f_d1 f_d2 g g_d1 g_d11 g_d12 g_d2 t y0 a0 b bu th thu v0 = 0 ∧
    Gen.adj_fgp_i_diagonal_11_en_gp_0_3 f f_d1 f_d2 g g_d1 g_d11 g_d12 g_d2 t y0 a0 b bu th thu v0 = 0 := by
  refine ⟨?_, ?_⟩ <;> simp [Gen.adj_fgp_i_diagonal_11_en_f_0_3, Gen.adj_fgp_i_diagonal_11_en_gp_0_3]

theorem adj_fgp_i_diagonal_11_en_pair (f : K → K → K → K) (f_d1 : K → K → K → K) (f_d2 : K → K → K → K) (g : K → K → K → K) (g_d1 : K → K → K → K) (g_d11 : K → K → K → K) (g_d12 : K → K → K → K) (g_d2 : K → K → K → K) (t y0 a0 b bu th thu v0 : K) :
    Gen.adj_fgp_i_diagonal_11_en_f_0_0 f f_d1 f_d2 g g_d1 g_d11 g_d12 g_d2 t y0 a0 b bu th thu v0
      = Gen.adj_f_i_diagonal_11_en_out_0_0 f f_d1 f_d11 f_d12 f_d2 f_d22 g g_d1 g_d11 g_d111 g_d112 g_d12 g_d122 g_d2 g_d22 t y0 a0 b bu th thu ∧
    Gen.adj_fgp_i_diagonal_11_en_f_0_1 f f_d1 f_d2 g g_d1 g_d11 g_d12 g_d2 t y0 a0 b bu th thu v0
      = Gen.adj_f_i_diagonal_11_en_out_0_1 f f_d1 f_d11 f_d12 f_d2 f_d22 g g_d1 g_d11 g_d111 g_d112 g_d12 g_d122 g_d2 g_d22 t y0 a0 b bu th thu ∧
    Gen.adj_fgp_i_diagonal_11_en_f_0_2 f f_d1 f_d2 g g_d1 g_d11 g_d12 g_d2 t y0 a0 b bu th thu v0
      = Gen.adj_f_i_diagonal_11_en_out_0_2 f f_d1 f_d11 f_d12 f_d2 f_d22 g g_d1 g_d11 g_d111 g_d112 g_d12 g_d122 g_d2 g_d22 t y0 a0 b bu th thu ∧
    Gen.adj_fgp_i_diagonal_11_en_f_0_3 f f_d1 f_d2 g g_d1 g_d11 g_d12 g_d2 t y0 a0 b bu th thu v0
      = Gen.adj_f_i_diagonal_11_en_out_0_3 f f_d1 f_d11 f_d12 f_d2 f_d22 g g_d1 g_d11 g_d111 g_d112 g_d12 g_d122 g_d2 g_d22 t y0 a0 b bu th thu ∧
    Gen.adj_fgp_i_diagonal_11_en_gp_0_0 f f_d1 f_d2 g g_d1 g_d11 g_d12 g_d2 t y0 a0 b bu th thu v0
      = Gen.adj_gp_i_diagonal_11_en_out_0_0 g g_d1 g_d11 g_d12 g_d2 g_d22 t y0 a0 b bu th thu v0 ∧
    Gen.adj_fgp_i_diagonal_11_en_gp_0_1 f f_d1 f_d2 g g_d1 g_d11 g_d12 g_d2 t y0 a0 b bu th thu v0
      = Gen.adj_gp_i_diagonal_11_en_out_0_1 g g_d1 g_d11 g_d12 g_d2 g_d22 t y0 a0 b bu th thu v0 ∧
    Gen.adj_fgp_i_diagonal_11_en_gp_0_2 f f_d1 f_d2 g g_d1 g_d11 g_d12 g_d2 t y0 a0 b bu th thu v0
      = Gen.adj_gp_i_diagonal_11_en_out_0_2 g g_d1 g_d11 g_d12 g_d2 g_d22 t y0 a0 b bu th thu v0 ∧
    Gen.adj_fgp_i_diagonal_11_en_gp_0_3 f f_d1 f_d2 g g_d1 g_d11 g_d12 g_d2 t y0 a0 b bu th thu v0
      = Gen.adj_gp_i_diagonal_11_en_out_0_3 g g_d1 g_d11 g_d12 g_d2 g_d22 t y0 a0 b bu th thu v0 := by
  refine ⟨?_, ?_, ?_, ?_, ?_, ?_, ?_, ?_⟩ <;> simp only [Gen.adj_fgp_i_diagonal_11_en_f_0_0, Gen.adj_f_i_diagonal_11_en_out_0_0, Gen.adj_fgp_i_diagonal_11_en_f_0_1, Gen.adj_f_i_diagonal_11_en_out_0_1, Gen.adj_fgp_i_diagonal_11_en_f_0_2, Gen.adj_f_i_diagonal_11_en_out_0_2, Gen.adj_fgp_i_diagonal_11_en_f_0_3, Gen.adj_f_i_diagonal_11_en_out_0_3, Gen.adj_fgp_i_diagonal_11_en_gp_0_0, Gen.adj_gp_i_diagonal_11_en_out_0_0, Gen.adj_fgp_i_diagonal_11_en_gp_0_1, Gen.adj_gp_i_diagonal_11_en_out_0_1, Gen.adj_fgp_i_diagonal_11_en_gp_0_2, Gen.adj_gp_i_diagonal_11_en_out_0_2, Gen.adj_fgp_i_diagonal_11_en_gp_0_3, Gen.adj_gp_i_diagonal_11_en_out_0_3] <;> ring

theorem adj_fgp_i_diagonal_11_en_graph (f : K → K → K → K) (f_d1 : K → K → K → K) (f_d2 : K → K → K → K) (g : K → K → K → K) (g_d1 : K → K → K → K) (g_d11 : K → K → K → K) (g_d12 : K → K → K → K) (g_d2 : K → K → K → K) (t y0 a0 b bu th thu v0 : K) :
    Gen.adj_fgp_i_diagonal_11_en_rg_f f f_d1 f_d2 g g_d1 g_d11 g_d12 g_d2 t y0 a0 b bu th thu v0 = 1 ∧
    Gen.adj_fgp_i_diagonal_11_en_leaf_f f f_d1 f_d2 g g_d1 g_d11 g_d12 g_d2 t y0 a0 b bu th thu v0 = 0 ∧
    Gen.adj_fgp_i_diagonal_11_en_rg_gp f f_d1 f_d2 g g_d1 g_d11 g_d12 g_d2 t y0 a0 b bu th thu v0 = 1 ∧
    Gen.adj_fgp_i_diagonal_11_en_leaf_gp f f_d1 f_d2 g g_d1 g_d11 g_d12 g_d2 t y0 a0 b bu th thu v0 = 0 ∧
    Gen.adj_fgp_i_diagonal_11_en_rg_z_after f f_d1 f_d2 g g_d1 g_d11 g_d12 g_d2 t y0 a0 b bu th thu v0 = 1 ∧
    Gen.adj_fgp_i_diagonal_11_en_leaf_z_after f f_d1 f_d2 g g_d1 g_d11 g_d12 g_d2 t y0 a0 b bu th thu v0 = 1 := by
  refine ⟨?_, ?_, ?_, ?_, ?_, ?_⟩ <;> simp only [Gen.adj_fgp_i_diagonal_11_en_rg_f, Gen.adj_fgp_i_diagonal_11_en_leaf_f, Gen.adj_fgp_i_diagonal_11_en_rg_gp, Gen.adj_fgp_i_diagonal_11_en_leaf_gp, Gen.adj_fgp_i_diagonal_11_en_rg_z_after, Gen.adj_fgp_i_diagonal_11_en_leaf_z_after]

theorem adj_gdg_i_diagonal_11_ng_spec (f : K → K → K → K) (f_d1 : K → K → K → K) (f_d2 : K → K → K → K) (g : K → K → K → K) (g_d1 : K → K → K → K) (g_d11 : K → K → K → K) (g_d12 : K → K → K → K) (g_d2 : K → K → K → K) (t y0 a0 b bu th thu w0 v0 : K) :
    Gen.adj_gdg_i_diagonal_11_ng_gp_0_0 g g_d1 g_d11 g_d12 g_d2 t y0 a0 b bu th thu w0 v0
      = gProdY (jet_diagonal_11 f f_d1 f_d2 g g_d1 g_d11 g_d12 g_d2 t y0 th) ![w0] 0 ∧
    Gen.adj_gdg_i_diagonal_11_ng_gp_0_1 g g_d1 g_d11 g_d12 g_d2 t y0 a0 b bu th thu w0 v0
      = gProdA (jet_diagonal_11 f f_d1 f_d2 g g_d1 g_d11 g_d12 g_d2 t y0 th) ![a0] ![w0] 0 ∧
    Gen.adj_gdg_i_diagonal_11_ng_gp_0_2 g g_d1 g_d11 g_d12 g_d2 t y0 a0 b bu th thu w0 v0
      = gProdTh (jet_diagonal_11 f f_d1 f_d2 g g_d1 g_d11 g_d12 g_d2 t y0 th) ![a0] ![w0] 0 ∧
    Gen.adj_gdg_i_diagonal_11_ng_gp_0_3 g g_d1 g_d11 g_d12 g_d2 t y0 a0 b bu th thu w0 v0
      = gProdTh (jet_diagonal_11 f f_d1 f_d2 g g_d1 g_d11 g_d12 g_d2 t y0 th) ![a0] ![w0] 1 ∧
    Gen.adj_gdg_i_diagonal_11_ng_gdg_0_0 g g_d1 g_d11 g_d12 g_d2 t y0 a0 b bu th thu w0 v0
      = gdgY (jet_diagonal_11 f f_d1 f_d2 g g_d1 g_d11 g_d12 g_d2 t y0 th) ![v0] 0 ∧
    Gen.adj_gdg_i_diagonal_11_ng_gdg_0_1 g g_d1 g_d11 g_d12 g_d2 t y0 a0 b bu th thu w0 v0
      = gdgA (jet_diagonal_11 f f_d1 f_d2 g g_d1 g_d11 g_d12 g_d2 t y0 th) ![a0] ![v0] 0 ∧
    Gen.adj_gdg_i_diagonal_11_ng_gdg_0_2 g g_d1 g_d11 g_d12 g_d2 t y0 a0 b bu th thu w0 v0
      = gdgTh (jet_diagonal_11 f f_d1 f_d2 g g_d1 g_d11 g_d12 g_d2 t y0 th) ![a0] ![v0] 0 ∧
    Gen.adj_gdg_i_diagonal_11_ng_gdg_0_3 g g_d1 g_d11 g_d12 g_d2 t y0 a0 b bu th thu w0 v0
      = gdgTh (jet_diagonal_11 f f_d1 f_d2 g g_d1 g_d11 g_d12 g_d2 t y0 th) ![a0] ![v0] 1 := by
  refine ⟨?_, ?_, ?_, ?_, ?_, ?_, ?_, ?_⟩ <;>
  simp [Gen.adj_gdg_i_diagonal_11_ng_gp_0_0, Gen.adj_gdg_i_diagonal_11_ng_gp_0_1, Gen.adj_gdg_i_diagonal_11_ng_gp_0_2, Gen.adj_gdg_i_diagonal_11_ng_gp_0_3, Gen.adj_gdg_i_diagonal_11_ng_gdg_0_0, Gen.adj_gdg_i_diagonal_11_ng_gdg_0_1, Gen.adj_gdg_i_diagonal_11_ng_gdg_0_2, Gen.adj_gdg_i_diagonal_11_ng_gdg_0_3, jet_diagonal_11, stratDriftY, stratDriftA, stratDriftTh, itoDriftY, itoDriftA, itoDriftTh, gProdY, gProdA, gProdTh, gdgY, gdgA, gdgTh, driftY, driftA, driftTh, diffY, diffA, diffTh, itoCorr, itoCorrY, itoCorrTh, fStrat, fStratY, fStratTh, colCorrY, colCorrA, colCorrTh, Fin.sum_univ_two, Fin.sum_univ_one, Fin.isValue, Matrix.cons_val_zero, Matrix.cons_val_one, Matrix.cons_val_fin_one, Matrix.head_cons] <;> ring

theorem adj_gdg_i_diagonal_11_ng_unused_param_zero (f : K → K → K → K) (f_d1 : K → K → K → K) (f_d2 : K → K → K → K) (g : K → K → K → K) (g_d1 : K → K → K → K) (g_d11 : K → K → K → K) (g_d12 : K → K → K → K) (g_d2 : K → K → K → K) (t y0 a0 b bu th thu w0 v0 : K) :
    Gen.adj_gdg_i_diagonal_11_ng_gp_0_3 g g_d1 g_d11 g_d12 g_d2 t y0 a0 b bu th thu w0 v0 = 0 ∧
    Gen.adj_gdg_i_diagonal_11_ng_gdg_0_3 g g_d1 g_d11 g_d12 g_d2 t y0 a0 b bu th thu w0 v0 = 0 := by
  refine ⟨?_, ?_⟩ <;> simp [Gen.adj_gdg_i_diagonal_11_ng_gp_0_3, Gen.adj_gdg_i_diagonal_11_ng_gdg_0_3]

theorem adj_gdg_i_diagonal_11_ng_pair (f : K → K → K → K) (f_d1 : K → K → K → K) (f_d2 : K → K → K → K) (g : K → K → K → K) (g_d1 : K → K → K → K) (g_d11 : K → K → K → K) (g_d12 : K → K → K → K) (g_d2 : K → K → K → K) (t y0 a0 b bu th thu w0 v0 : K) :
    Gen.adj_gdg_i_diagonal_11_ng_gp_0_0 g g_d1 g_d11 g_d12 g_d2 t y0 a0 b bu th thu w0 v0
      = Gen.adj_gp_i_diagonal_11_ng_out_0_0 g g_d1 g_d2 t y0 a0 b bu th thu w0 ∧
    Gen.adj_gdg_i_diagonal_11_ng_gp_0_1 g g_d1 g_d11 g_d12 g_d2 t y0 a0 b bu th thu w0 v0
      = Gen.adj_gp_i_diagonal_11_ng_out_0_1 g g_d1 g_d2 t y0 a0 b bu th thu w0 ∧
    Gen.adj_gdg_i_diagonal_11_ng_gp_0_2 g g_d1 g_d11 g_d12 g_d2 t y0 a0 b bu th thu w0 v0
      = Gen.adj_gp_i_diagonal_11_ng_out_0_2 g g_d1 g_d2 t y0 a0 b bu th thu w0 ∧
    Gen.adj_gdg_i_diagonal_11_ng_gp_0_3 g g_d1 g_d11 g_d12 g_d2 t y0 a0 b bu th thu w0 v0
      = Gen.adj_gp_i_diagonal_11_ng_out_0_3 g g_d1 g_d2 t y0 a0 b bu th thu w0 := by
  refine ⟨?_, ?_, ?_, ?_⟩ <;> simp only [Gen.adj_gdg_i_diagonal_11_ng_gp_0_0, Gen.adj_gp_i_diagonal_11_ng_out_0_0, Gen.adj_gdg_i_diagonal_11_ng_gp_0_1, Gen.adj_gp_i_diagonal_11_ng_out_0_1, Gen.adj_gdg_i_diagonal_11_ng_gp_0_2, Gen.adj_gp_i_diagonal_11_ng_out_0_2, Gen.adj_gdg_i_diagonal_11_ng_gp_0_3, Gen.adj_gp_i_diagonal_11_ng_out_0_3] <;> ring

theorem adj_gdg_i_diagonal_11_ng_graph (f : K → K → K → K) (f_d1 : K → K → K → K) (f_d2 : K → K → K → K) (g : K → K → K → K) (g_d1 : K → K → K → K) (g_d11 : K → K → K → K) (g_d12 : K → K → K → K) (g_d2 : K → K → K → K) (t y0 a0 b bu th thu w0 v0 : K) :
    Gen.adj_gdg_i_diagonal_11_ng_rg_gp g g_d1 g_d11 g_d12 g_d2 t y0 a0 b bu th thu w0 v0 = 0 ∧
    Gen.adj_gdg_i_diagonal_11_ng_leaf_gp g g_d1 g_d11 g_d12 g_d2 t y0 a0 b bu th thu w0 v0 = 1 ∧
    Gen.adj_gdg_i_diagonal_11_ng_rg_gdg g g_d1 g_d11 g_d12 g_d2 t y0 a0 b bu th thu w0 v0 = 0 ∧
    Gen.adj_gdg_i_diagonal_11_ng_leaf_gdg g g_d1 g_d11 g_d12 g_d2 t y0 a0 b bu th thu w0 v0 = 1 ∧
    Gen.adj_gdg_i_diagonal_11_ng_rg_z_after g g_d1 g_d11 g_d12 g_d2 t y0 a0 b bu th thu w0 v0 = 0 ∧
    Gen.adj_gdg_i_diagonal_11_ng_leaf_z_after g g_d1 g_d11 g_d12 g_d2 t y0 a0 b bu th thu w0 v0 = 1 := by
  refine ⟨?_, ?_, ?_, ?_, ?_, ?_⟩ <;> simp only [Gen.adj_gdg_i_diagonal_11_ng_rg_gp, Gen.adj_gdg_i_diagonal_11_ng_leaf_gp, Gen.adj_gdg_i_diagonal_11_ng_rg_gdg, Gen.adj_gdg_i_diagonal_11_ng_leaf_gdg, Gen.adj_gdg_i_diagonal_11_ng_rg_z_after, Gen.adj_gdg_i_diagonal_11_ng_leaf_z_after]

theorem adj_gdg_i_diagonal_11_en_spec (f : K → K → K → K) (f_d1 : K → K → K → K) (f_d2 : K → K → K → K) (g : K → K → K → K) (g_d1 : K → K → K → K) (g_d11 : K → K → K → K) (g_d111 : K → K → K → K) (g_d112 : K → K → K → K) (g_d12 : K → K → K → K) (g_d122 : K → K → K → K) (g_d2 : K → K → K → K) (g_d22 : K → K → K → K) (t y0 a0 b bu th thu w0 v0 : K) :
    Gen.adj_gdg_i_diagonal_11_en_gp_0_0 g g_d1 g_d11 g_d111 g_d112 g_d12 g_d122 g_d2 g_d22 t y0 a0 b bu th thu w0 v0
      = gProdY (jet_diagonal_11 f f_d1 f_d2 g g_d1 g_d11 g_d12 g_d2 t y0 th) ![w0] 0 ∧
    Gen.adj_gdg_i_diagonal_11_en_gp_0_1 g g_d1 g_d11 g_d111 g_d112 g_d12 g_d122 g_d2 g_d22 t y0 a0 b bu th thu w0 v0
      = gProdA (jet_diagonal_11 f f_d1 f_d2 g g_d1 g_d11 g_d12 g_d2 t y0 th) ![a0] ![w0] 0 ∧
    Gen.adj_gdg_i_diagonal_11_en_gp_0_2 g g_d1 g_d11 g_d111 g_d112 g_d12 g_d122 g_d2 g_d22 t y0 a0 b bu th thu w0 v0
      = gProdTh (jet_diagonal_11 f f_d1 f_d2 g g_d1 g_d11 g_d12 g_d2 t y0 th) ![a0] ![w0] 0 ∧
    Gen.adj_gdg_i_diagonal_11_en_gp_0_3 g g_d1 g_d11 g_d111 g_d112 g_d12 g_d122 g_d2 g_d22 t y0 a0 b bu th thu w0 v0
      = gProdTh (jet_diagonal_11 f f_d1 f_d2 g g_d1 g_d11 g_d12 g_d2 t y0 th) ![a0] ![w0] 1 ∧
    Gen.adj_gdg_i_diagonal_11_en_gdg_0_0 g g_d1 g_d11 g_d111 g_d112 g_d12 g_d122 g_d2 g_d22 t y0 a0 b bu th thu w0 v0
      = gdgY (jet_diagonal_11 f f_d1 f_d2 g g_d1 g_d11 g_d12 g_d2 t y0 th) ![v0] 0 ∧
    Gen.adj_gdg_i_diagonal_11_en_gdg_0_1 g g_d1 g_d11 g_d111 g_d112 g_d12 g_d122 g_d2 g_d22 t y0 a0 b bu th thu w0 v0
      = gdgA (jet_diagonal_11 f f_d1 f_d2 g g_d1 g_d11 g_d12 g_d2 t y0 th) ![a0] ![v0] 0 ∧
    Gen.adj_gdg_i_diagonal_11_en_gdg_0_2 g g_d1 g_d11 g_d111 g_d112 g_d12 g_d122 g_d2 g_d22 t y0 a0 b bu th thu w0 v0
      = gdgTh (jet_diagonal_11 f f_d1 f_d2 g g_d1 g_d11 g_d12 g_d2 t y0 th) ![a0] ![v0] 0 ∧
    Gen.adj_gdg_i_diagonal_11_en_gdg_0_3 g g_d1 g_d11 g_d111 g_d112 g_d12 g_d122 g_d2 g_d22 t y0 a0 b bu th thu w0 v0
      = gdgTh (jet_diagonal_11 f f_d1 f_d2 g g_d1 g_d11 g_d12 g_d2 t y0 th) ![a0] ![v0] 1 := by
  refine ⟨?_, ?_, ?_, ?_, ?_, ?_, ?_, ?_⟩ <;>
  simp [Gen.adj_gdg_i_diagonal_11_en_gp_0_0, Gen.adj_gdg_i_diagonal_11_en_gp_0_1, Gen.adj_gdg_i_diagonal_11_en_gp_0_2, Gen.adj_gdg_i_diagonal_11_en_gp_0_3, Gen.adj_gdg_i_diagonal_11_en_gdg_0_0, Gen.adj_gdg_i_diagonal_11_en_gdg_0_1, Gen.adj_gdg_i_diagonal_11_en_gdg_0_2, Gen.adj_gdg_i_diagonal_11_en_gdg_0_3, jet_diagonal_11, stratDriftY, stratDriftA, stratDriftTh, itoDriftY, itoDriftA, itoDriftTh, gProdY, gProdA, gProdTh, gdgY, gdgA, gdgTh, driftY, driftA, driftTh, diffY, diffA, diffTh, itoCorr, itoCorrY, itoCorrTh, fStrat, fStratY, fStratTh, colCorrY, colCorrA, colCorrTh, Fin.sum_univ_two, Fin.sum_univ_one, Fin.isValue, Matrix.cons_val_zero, Matrix.cons_val_one, Matrix.cons_val_fin_one, Matrix.head_cons] <;> ring

theorem adj_gdg_i_diagonal_11_en_unused_param_zero (f : K → K → K → K) (f_d1 : K → K → K → K) (f_d2 : K → K → K → K) (g : K → K → K → K) (g_d1 : K → K → K → K) (g_d11 : K → K → K → K) (g_d111 : K → K → K → K) (g_d112 : K → K → K → K) (g_d12 : K → K → K → K) (g_d122 : K → K → K → K) (g_d2 : K → K → K → K) (g_d22 : K → K → K → K) (t y0 a0 b bu th thu w0 v0 : K) :
    Gen.adj_gdg_i_diagonal_11_en_gp_0_3 g g_d1 g_d11 g_d111 g_d112 g_d12 g_d122 g_d2 g_d22 t y0 a0 b bu th thu w0 v0 = 0 ∧
    Gen.adj_gdg_i_diagonal_11_en_gdg_0_3 g g_d1 g_d11 g_d111 g_d112 g_d12 g_d122 g_d2 g_d22 t y0 a0 b bu th thu w0 v0 = 0 := by
  refine ⟨?_, ?_⟩ <;> simp [Gen.adj_gdg_i_diagonal_11_en_gp_0_3, Gen.adj_gdg_i_diagonal_11_en_gdg_0_3]

theorem adj_gdg_i_diagonal_11_en_pair (f : K → K → K → K) (f_d1 : K → K → K → K) (f_d2 : K → K → K → K) (g : K → K → K → K) (g_d1 : K → K → K → K) (g_d11 : K → K → K → K) (g_d111 : K → K → K → K) (g_d112 : K → K → K → K) (g_d12 : K → K → K → K) (g_d122 : K → K → K → K) (g_d2 : K → K → K → K) (g_d22 : K → K → K → K) (t y0 a0 b bu th thu w0 v0 : K) :
    Gen.adj_gdg_i_diagonal_11_en_gp_0_0 g g_d1 g_d11 g_d111 g_d112 g_d12 g_d122 g_d2 g_d22 t y0 a0 b bu th thu w0 v0
      = Gen.adj_gp_i_diagonal_11_en_out_0_0 g g_d1 g_d11 g_d12 g_d2 g_d22 t y0 a0 b bu th thu w0 ∧
    Gen.adj_gdg_i_diagonal_11_en_gp_0_1 g g_d1 g_d11 g_d111 g_d112 g_d12 g_d122 g_d2 g_d22 t y0 a0 b bu th thu w0 v0
      = Gen.adj_gp_i_diagonal_11_en_out_0_1 g g_d1 g_d11 g_d12 g_d2 g_d22 t y0 a0 b bu th thu w0 ∧
    Gen.adj_gdg_i_diagonal_11_en_gp_0_2 g g_d1 g_d11 g_d111 g_d112 g_d12 g_d122 g_d2 g_d22 t y0 a0 b bu th thu w0 v0
      = Gen.adj_gp_i_diagonal_11_en_out_0_2 g g_d1 g_d11 g_d12 g_d2 g_d22 t y0 a0 b bu th thu w0 ∧
    Gen.adj_gdg_i_diagonal_11_en_gp_0_3 g g_d1 g_d11 g_d111 g_d112 g_d12 g_d122 g_d2 g_d22 t y0 a0 b bu th thu w0 v0
      = Gen.adj_gp_i_diagonal_11_en_out_0_3 g g_d1 g_d11 g_d12 g_d2 g_d22 t y0 a0 b bu th thu w0 := by
  refine ⟨?_, ?_, ?_, ?_⟩ <;> simp only [Gen.adj_gdg_i_diagonal_11_en_gp_0_0, Gen.adj_gp_i_diagonal_11_en_out_0_0, Gen.adj_gdg_i_diagonal_11_en_gp_0_1, Gen.adj_gp_i_diagonal_11_en_out_0_1, Gen.adj_gdg_i_diagonal_11_en_gp_0_2, Gen.adj_gp_i_diagonal_11_en_out_0_2, Gen.adj_gdg_i_diagonal_11_en_gp_0_3, Gen.adj_gp_i_diagonal_11_en_out_0_3] <;> ring

theorem adj_gdg_i_diagonal_11_en_graph (f : K → K → K → K) (f_d1 : K → K → K → K) (f_d2 : K → K → K → K) (g : K → K → K → K) (g_d1 : K → K → K → K) (g_d11 : K → K → K → K) (g_d111 : K → K → K → K) (g_d112 : K → K → K → K) (g_d12 : K → K → K → K) (g_d122 : K → K → K → K) (g_d2 : K → K → K → K) (g_d22 : K → K → K → K) (t y0 a0 b bu th thu w0 v0 : K) :
    Gen.adj_gdg_i_diagonal_11_en_rg_gp g g_d1 g_d11 g_d111 g_d112 g_d12 g_d122 g_d2 g_d22 t y0 a0 b bu th thu w0 v0 = 1 ∧
    Gen.adj_gdg_i_diagonal_11_en_leaf_gp g g_d1 g_d11 g_d111 g_d112 g_d12 g_d122 g_d2 g_d22 t y0 a0 b bu th thu w0 v0 = 0 ∧
    Gen.adj_gdg_i_diagonal_11_en_rg_gdg g g_d1 g_d11 g_d111 g_d112 g_d12 g_d122 g_d2 g_d22 t y0 a0 b bu th thu w0 v0 = 1 ∧
    Gen.adj_gdg_i_diagonal_11_en_leaf_gdg g g_d1 g_d11 g_d111 g_d112 g_d12 g_d122 g_d2 g_d22 t y0 a0 b bu th thu w0 v0 = 0 ∧
    Gen.adj_gdg_i_diagonal_11_en_rg_z_after g g_d1 g_d11 g_d111 g_d112 g_d12 g_d122 g_d2 g_d22 t y0 a0 b bu th thu w0 v0 = 1 ∧
    Gen.adj_gdg_i_diagonal_11_en_leaf_z_after g g_d1 g_d11 g_d111 g_d112 g_d12 g_d122 g_d2 g_d22 t y0 a0 b bu th thu w0 v0 = 1 := by
  refine ⟨?_, ?_, ?_, ?_, ?_, ?_⟩ <;> simp only [Gen.adj_gdg_i_diagonal_11_en_rg_gp, Gen.adj_gdg_i_diagonal_11_en_leaf_gp, Gen.adj_gdg_i_diagonal_11_en_rg_gdg, Gen.adj_gdg_i_diagonal_11_en_leaf_gdg, Gen.adj_gdg_i_diagonal_11_en_rg_z_after, Gen.adj_gdg_i_diagonal_11_en_leaf_z_after]

theorem adj_f_i_diagonal_22_ng_spec (f0 : K → K → K → K → K) (f0_d1 : K → K → K → K → K) (f0_d2 : K → K → K → K → K) (f0_d3 : K → K → K → K → K) (f1 : K → K → K → K → K) (f1_d1 : K → K → K → K → K) (f1_d2 : K → K → K → K → K) (f1_d3 : K → K → K → K → K) (g0 : K → K → K → K) (g0_d1 : K → K → K → K) (g0_d11 : K → K → K → K) (g0_d12 : K → K → K → K) (g0_d2 : K → K → K → K) (g1 : K → K → K → K) (g1_d1 : K → K → K → K) (g1_d11 : K → K → K → K) (g1_d12 : K → K → K → K) (g1_d2 : K → K → K → K) (t y0 y1 a0 a1 b bu th thu : K) :
    Gen.adj_f_i_diagonal_22_ng_out_0_0 f0 f0_d1 f0_d2 f0_d3 f1 f1_d1 f1_d2 f1_d3 g0 g0_d1 g0_d11 g0_d12 g0_d2 g1 g1_d1 g1_d11 g1_d12 g1_d2 t y0 y1 a0 a1 b bu th thu
      = itoDriftY (jet_diagonal_22 f0 f0_d1 f0_d2 f0_d3 f1 f1_d1 f1_d2 f1_d3 g0 g0_d1 g0_d11 g0_d12 g0_d2 g1 g1_d1 g1_d11 g1_d12 g1_d2 t y0 y1 th) 0 ∧
    Gen.adj_f_i_diagonal_22_ng_out_0_1 f0 f0_d1 f0_d2 f0_d3 f1 f1_d1 f1_d2 f1_d3 g0 g0_d1 g0_d11 g0_d12 g0_d2 g1 g1_d1 g1_d11 g1_d12 g1_d2 t y0 y1 a0 a1 b bu th thu
      = itoDriftY (jet_diagonal_22 f0 f0_d1 f0_d2 f0_d3 f1 f1_d1 f1_d2 f1_d3 g0 g0_d1 g0_d11 g0_d12 g0_d2 g1 g1_d1 g1_d11 g1_d12 g1_d2 t y0 y1 th) 1 ∧
    Gen.adj_f_i_diagonal_22_ng_out_0_2 f0 f0_d1 f0_d2 f0_d3 f1 f1_d1 f1_d2 f1_d3 g0 g0_d1 g0_d11 g0_d12 g0_d2 g1 g1_d1 g1_d11 g1_d12 g1_d2 t y0 y1 a0 a1 b bu th thu
      = itoDriftA (jet_diagonal_22 f0 f0_d1 f0_d2 f0_d3 f1 f1_d1 f1_d2 f1_d3 g0 g0_d1 g0_d11 g0_d12 g0_d2 g1 g1_d1 g1_d11 g1_d12 g1_d2 t y0 y1 th) ![a0, a1] 0 ∧
    Gen.adj_f_i_diagonal_22_ng_out_0_3 f0 f0_d1 f0_d2 f0_d3 f1 f1_d1 f1_d2 f1_d3 g0 g0_d1 g0_d11 g0_d12 g0_d2 g1 g1_d1 g1_d11 g1_d12 g1_d2 t y0 y1 a0 a1 b bu th thu
      = itoDriftA (jet_diagonal_22 f0 f0_d1 f0_d2 f0_d3 f1 f1_d1 f1_d2 f1_d3 g0 g0_d1 g0_d11 g0_d12 g0_d2 g1 g1_d1 g1_d11 g1_d12 g1_d2 t y0 y1 th) ![a0, a1] 1 ∧
    Gen.adj_f_i_diagonal_22_ng_out_0_4 f0 f0_d1 f0_d2 f0_d3 f1 f1_d1 f1_d2 f1_d3 g0 g0_d1 g0_d11 g0_d12 g0_d2 g1 g1_d1 g1_d11 g1_d12 g1_d2 t y0 y1 a0 a1 b bu th thu
      = itoDriftTh (jet_diagonal_22 f0 f0_d1 f0_d2 f0_d3 f1 f1_d1 f1_d2 f1_d3 g0 g0_d1 g0_d11 g0_d12 g0_d2 g1 g1_d1 g1_d11 g1_d12 g1_d2 t y0 y1 th) ![a0, a1] 0 ∧
    Gen.adj_f_i_diagonal_22_ng_out_0_5 f0 f0_d1 f0_d2 f0_d3 f1 f1_d1 f1_d2 f1_d3 g0 g0_d1 g0_d11 g0_d12 g0_d2 g1 g1_d1 g1_d11 g1_d12 g1_d2 t y0 y1 a0 a1 b bu th thu
      = itoDriftTh (jet_diagonal_22 f0 f0_d1 f0_d2 f0_d3 f1 f1_d1 f1_d2 f1_d3 g0 g0_d1 g0_d11 g0_d12 g0_d2 g1 g1_d1 g1_d11 g1_d12 g1_d2 t y0 y1 th) ![a0, a1] 1 := by
  refine ⟨?_, ?_, ?_, ?_, ?_, ?_⟩ <;>
  simp [Gen.adj_f_i_diagonal_22_ng_out_0_0, Gen.adj_f_i_diagonal_22_ng_out_0_1, Gen.adj_f_i_diagonal_22_ng_out_0_2, Gen.adj_f_i_diagonal_22_ng_out_0_3, Gen.adj_f_i_diagonal_22_ng_out_0_4, Gen.adj_f_i_diagonal_22_ng_out_0_5, jet_diagonal_22, stratDriftY, stratDriftA, stratDriftTh, itoDriftY, itoDriftA, itoDriftTh, gProdY, gProdA, gProdTh, gdgY, gdgA, gdgTh, driftY, driftA, driftTh, diffY, diffA, diffTh, itoCorr, itoCorrY, itoCorrTh, fStrat, fStratY, fStratTh, colCorrY, colCorrA, colCorrTh, Fin.sum_univ_two, Fin.sum_univ_one, Fin.isValue, Matrix.cons_val_zero, Matrix.cons_val_one, Matrix.cons_val_fin_one, Matrix.head_cons] <;> ring

theorem adj_f_i_diagonal_22_ng_unused_param_zero (f0 : K → K → K → K → K) (f0_d1 : K → K → K → K → K) (f0_d2 : K → K → K → K → K) (f0_d3 : K → K → K → K → K) (f1 : K → K → K → K → K) (f1_d1 : K → K → K → K → K) (f1_d2 : K → K → K → K → K) (f1_d3 : K → K → K → K → K) (g0 : K → K → K → K) (g0_d1 : K → K → K → K) (g0_d11 : K → K → K → K) (g0_d12 : K → K → K → K) (g0_d2 : K → K → K → K) (g1 : K → K → K → K) (g1_d1 : K → K → K → K) (g1_d11 : K → K → K → K) (g1_d12 : K → K → K → K) (g1_d2 : K → K → K → K) (t y0 y1 a0 a1 b bu th thu : K) :
    Gen.adj_f_i_diagonal_22_ng_out_0_5 f0 f0_d1 f0_d2 f0_d3 f1 f1_d1 f1_d2 f1_d3 g0 g0_d1 g0_d11 g0_d12 g0_d2 g1 g1_d1 g1_d11 g1_d12 g1_d2 t y0 y1 a0 a1 b bu th thu = 0 := by
  simp [Gen.adj_f_i_diagonal_22_ng_out_0_5]

theorem adj_f_i_diagonal_22_ng_graph (f0 : K → K → K → K → K) (f0_d1 : K → K → K → K → K) (f0_d2 : K → K → K → K → K) (f0_d3 : K → K → K → K → K) (f1 : K → K → K → K → K) (f1_d1 : K → K → K → K → K) (f1_d2 : K → K → K → K → K) (f1_d3 : K → K → K → K → K) (g0 : K → K → K → K) (g0_d1 : K → K → K → K) (g0_d11 : K → K → K → K) (g0_d12 : K → K → K → K) (g0_d2 : K → K → K → K) (g1 : K → K → K → K) (g1_d1 : K → K → K → K) (g1_d11 : K → K → K → K) (g1_d12 : K → K → K → K) (g1_d2 : K → K → K → K) (t y0 y1 a0 a1 b bu th thu : K) :
    Gen.adj_f_i_diagonal_22_ng_rg_out f0 f0_d1 f0_d2 f0_d3 f1 f1_d1 f1_d2 f1_d3 g0 g0_d1 g0_d11 g0_d12 g0_d2 g1 g1_d1 g1_d11 g1_d12 g1_d2 t y0 y1 a0 a1 b bu th thu = 0 ∧
    Gen.adj_f_i_diagonal_22_ng_leaf_out f0 f0_d1 f0_d2 f0_d3 f1 f1_d1 f1_d2 f1_d3 g0 g0_d1 g0_d11 g0_d12 g0_d2 g1 g1_d1 g1_d11 g1_d12 g1_d2 t y0 y1 a0 a1 b bu th thu = 1 ∧
    Gen.adj_f_i_diagonal_22_ng_rg_z_after f0 f0_d1 f0_d2 f0_d3 f1 f1_d1 f1_d2 f1_d3 g0 g0_d1 g0_d11 g0_d12 g0_d2 g1 g1_d1 g1_d11 g1_d12 g1_d2 t y0 y1 a0 a1 b bu th thu = 0 ∧
    Gen.adj_f_i_diagonal_22_ng_leaf_z_after f0 f0_d1 f0_d2 f0_d3 f1 f1_d1 f1_d2 f1_d3 g0 g0_d1 g0_d11 g0_d12 g0_d2 g1 g1_d1 g1_d11 g1_d12 g1_d2 t y0 y1 a0 a1 b bu th thu = 1 := by
  refine ⟨?_, ?_, ?_, ?_⟩ <;> simp only [Gen.adj_f_i_diagonal_22_ng_rg_out, Gen.adj_f_i_diagonal_22_ng_leaf_out, Gen.adj_f_i_diagonal_22_ng_rg_z_after, Gen.adj_f_i_diagonal_22_ng_leaf_z_after]

theorem adj_f_i_diagonal_22_en_spec (f0 : K → K → K → K → K) (f0_d1 : K → K → K → K → K) (f0_d2 : K → K → K → K → K) (f0_d3 : K → K → K → K → K) (f1 : K → K → K → K → K) (f1_d1 : K → K → K → K → K) (f1_d2 : K → K → K → K → K) (f1_d3 : K → K → K → K → K) (g0 : K → K → K → K) (g0_d1 : K → K → K → K) (g0_d11 : K → K → K → K) (g0_d12 : K → K → K → K) (g0_d2 : K → K → K → K) (g1 : K → K → K → K) (g1_d1 : K → K → K → K) (g1_d11 : K → K → K → K) (g1_d12 : K → K → K → K) (g1_d2 : K → K → K → K) (t y0 y1 a0 a1 b bu th thu : K) :
    Gen.adj_f_i_diagonal_22_en_out_0_0 f0 f0_d1 f0_d2 f0_d3 f1 f1_d1 f1_d2 f1_d3 g0 g0_d1 g0_d11 g0_d12 g0_d2 g1 g1_d1 g1_d11 g1_d12 g1_d2 t y0 y1 a0 a1 b bu th thu
      = itoDriftY (jet_diagonal_22 f0 f0_d1 f0_d2 f0_d3 f1 f1_d1 f1_d2 f1_d3 g0 g0_d1 g0_d11 g0_d12 g0_d2 g1 g1_d1 g1_d11 g1_d12 g1_d2 t y0 y1 th) 0 ∧
    Gen.adj_f_i_diagonal_22_en_out_0_1 f0 f0_d1 f0_d2 f0_d3 f1 f1_d1 f1_d2 f1_d3 g0 g0_d1 g0_d11 g0_d12 g0_d2 g1 g1_d1 g1_d11 g1_d12 g1_d2 t y0 y1 a0 a1 b bu th thu
      = itoDriftY (jet_diagonal_22 f0 f0_d1 f0_d2 f0_d3 f1 f1_d1 f1_d2 f1_d3 g0 g0_d1 g0_d11 g0_d12 g0_d2 g1 g1_d1 g1_d11 g1_d12 g1_d2 t y0 y1 th) 1 ∧
    Gen.adj_f_i_diagonal_22_en_out_0_2 f0 f0_d1 f0_d2 f0_d3 f1 f1_d1 f1_d2 f1_d3 g0 g0_d1 g0_d11 g0_d12 g0_d2 g1 g1_d1 g1_d11 g1_d12 g1_d2 t y0 y1 a0 a1 b bu th thu
      = itoDriftA (jet_diagonal_22 f0 f0_d1 f0_d2 f0_d3 f1 f1_d1 f1_d2 f1_d3 g0 g0_d1 g0_d11 g0_d12 g0_d2 g1 g1_d1 g1_d11 g1_d12 g1_d2 t y0 y1 th) ![a0, a1] 0 ∧
    Gen.adj_f_i_diagonal_22_en_out_0_3 f0 f0_d1 f0_d2 f0_d3 f1 f1_d1 f1_d2 f1_d3 g0 g0_d1 g0_d11 g0_d12 g0_d2 g1 g1_d1 g1_d11 g1_d12 g1_d2 t y0 y1 a0 a1 b bu th thu
      = itoDriftA (jet_diagonal_22 f0 f0_d1 f0_d2 f0_d3 f1 f1_d1 f1_d2 f1_d3 g0 g0_d1 g0_d11 g0_d12 g0_d2 g1 g1_d1 g1_d11 g1_d12 g1_d2 t y0 y1 th) ![a0, a1] 1 ∧
    Gen.adj_f_i_diagonal_22_en_out_0_4 f0 f0_d1 f0_d2 f0_d3 f1 f1_d1 f1_d2 f1_d3 g0 g0_d1 g0_d11 g0_d12 g0_d2 g1 g1_d1 g1_d11 g1_d12 g1_d2 t y0 y1 a0 a1 b bu th thu
      = itoDriftTh (jet_diagonal_22 f0 f0_d1 f0_d2 f0_d3 f1 f1_d1 f1_d2 f1_d3 g0 g0_d1 g0_d11 g0_d12 g0_d2 g1 g1_d1 g1_d11 g1_d12 g1_d2 t y0 y1 th) ![a0, a1] 0 ∧
    Gen.adj_f_i_diagonal_22_en_out_0_5 f0 f0_d1 f0_d2 f0_d3 f1 f1_d1 f1_d2 f1_d3 g0 g0_d1 g0_d11 g0_d12 g0_d2 g1 g1_d1 g1_d11 g1_d12 g1_d2 t y0 y1 a0 a1 b bu th thu
      = itoDriftTh (jet_diagonal_22 f0 f0_d1 f0_d2 f0_d3 f1 f1_d1 f1_d2 f1_d3 g0 g0_d1 g0_d11 g0_d12 g0_d2 g1 g1_d1 g1_d11 g1_d12 g1_d2 t y0 y1 th) ![a0, a1] 1 := by
  refine ⟨?_, ?_, ?_, ?_, ?_, ?_⟩ <;>
  simp [Gen.adj_f_i_diagonal_22_en_out_0_0, Gen.adj_f_i_diagonal_22_en_out_0_1, Gen.adj_f_i_diagonal_22_en_out_0_2, Gen.adj_f_i_diagonal_22_en_out_0_3, Gen.adj_f_i_diagonal_22_en_out_0_4, Gen.adj_f_i_diagonal_22_en_out_0_5, jet_diagonal_22, stratDriftY, stratDriftA, stratDriftTh, itoDriftY, itoDriftA, itoDriftTh, gProdY, gProdA, gProdTh, gdgY, gdgA, gdgTh, driftY, driftA, driftTh, diffY, diffA, diffTh, itoCorr, itoCorrY, itoCorrTh, fStrat, fStratY, fStratTh, colCorrY, colCorrA, colCorrTh, Fin.sum_univ_two, Fin.sum_univ_one, Fin.isValue, Matrix.cons_val_zero, Matrix.cons_val_one, Matrix.cons_val_fin_one, Matrix.head_cons] <;> ring

theorem adj_f_i_diagonal_22_en_unused_param_zero (f0 : K → K → K → K → K) (f0_d1 : K → K → K → K → K) (f0_d2 : K → K → K → K → K) (f0_d3 : K → K → K → K → K) (f1 : K → K → K → K → K) (f1_d1 : K → K → K → K → K) (f1_d2 : K → K → K → K → K) (f1_d3 : K → K → K → K → K) (g0 : K → K → K → K) (g0_d1 : K → K → K → K) (g0_d11 : K → K → K → K) (g0_d12 : K → K → K → K) (g0_d2 : K → K → K → K) (g1 : K → K → K → K) (g1_d1 : K → K → K → K) (g1_d11 : K → K → K → K) (g1_d12 : K → K → K → K) (g1_d2 : K → K → K → K) (t y0 y1 a0 a1 b bu th thu : K) :
    Gen.adj_f_i_diagonal_22_en_out_0_5 f0 f0_d1 f0_d2 f0_d3 f1 f1_d1 f1_d2 f1_d3 g0 g0_d1 g0_d11 g0_d12 g0_d2 g1 g1_d1 g1_d11 g1_d12 g1_d2 t y0 y1 a0 a1 b bu th thu = 0 := by
  simp [Gen.adj_f_i_diagonal_22_en_out_0_5]

theorem adj_f_i_diagonal_22_en_graph (f0 : K → K → K → K → K) (f0_d1 : K → K → K → K → K) (f0_d2 : K → K → K → K → K) (f0_d3 : K → K → K → K → K) (f1 : K → K → K → K → K) (f1_d1 : K → K → K → K → K) (f1_d2 : K → K → K → K → K) (f1_d3 : K → K → K → K → K) (g0 : K → K → K → K) (g0_d1 : K → K → K → K) (g0_d11 : K → K → K → K) (g0_d12 : K → K → K → K) (g0_d2 : K → K → K → K) (g1 : K → K → K → K) (g1_d1 : K → K → K → K) (g1_d11 : K → K → K → K) (g1_d12 : K → K → K → K) (g1_d2 : K → K → K → K) (t y0 y1 a0 a1 b bu th thu : K) :
    Gen.adj_f_i_diagonal_22_en_rg_out f0 f0_d1 f0_d2 f0_d3 f1 f1_d1 f1_d2 f1_d3 g0 g0_d1 g0_d11 g0_d12 g0_d2 g1 g1_d1 g1_d11 g1_d12 g1_d2 t y0 y1 a0 a1 b bu th thu = 1 ∧
    Gen.adj_f_i_diagonal_22_en_leaf_out f0 f0_d1 f0_d2 f0_d3 f1 f1_d1 f1_d2 f1_d3 g0 g0_d1 g0_d11 g0_d12 g0_d2 g1 g1_d1 g1_d11 g1_d12 g1_d2 t y0 y1 a0 a1 b bu th thu = 0 ∧
    Gen.adj_f_i_diagonal_22_en_rg_z_after f0 f0_d1 f0_d2 f0_d3 f1 f1_d1 f1_d2 f1_d3 g0 g0_d1 g0_d11 g0_d12 g0_d2 g1 g1_d1 g1_d11 g1_d12 g1_d2 t y0 y1 a0 a1 b bu th thu = 1 ∧
    Gen.adj_f_i_diagonal_22_en_leaf_z_after f0 f0_d1 f0_d2 f0_d3 f1 f1_d1 f1_d2 f1_d3 g0 g0_d1 g0_d11 g0_d12 g0_d2 g1 g1_d1 g1_d11 g1_d12 g1_d2 t y0 y1 a0 a1 b bu th thu = 1 := by
  refine ⟨?_, ?_, ?_, ?_⟩ <;> simp only [Gen.adj_f_i_diagonal_22_en_rg_out, Gen.adj_f_i_diagonal_22_en_leaf_out, Gen.adj_f_i_diagonal_22_en_rg_z_after, Gen.adj_f_i_diagonal_22_en_leaf_z_after]

theorem adj_gp_i_diagonal_22_ng_spec (f0 : K → K → K → K → K) (f0_d1 : K → K → K → K → K) (f0_d2 : K → K → K → K → K) (f0_d3 : K → K → K → K → K) (f1 : K → K → K → K → K) (f1_d1 : K → K → K → K → K) (f1_d2 : K → K → K → K → K) (f1_d3 : K → K → K → K → K) (g0 : K → K → K → K) (g0_d1 : K → K → K → K) (g0_d11 : K → K → K → K) (g0_d12 : K → K → K → K) (g0_d2 : K → K → K → K) (g1 : K → K → K → K) (g1_d1 : K → K → K → K) (g1_d11 : K → K → K → K) (g1_d12 : K → K → K → K) (g1_d2 : K → K → K → K) (t y0 y1 a0 a1 b bu th thu v0 v1 : K) :
    Gen.adj_gp_i_diagonal_22_ng_out_0_0 g0 g0_d1 g0_d2 g1 g1_d1 g1_d2 t y0 y1 a0 a1 b bu th thu v0 v1
      = gProdY (jet_diagonal_22 f0 f0_d1 f0_d2 f0_d3 f1 f1_d1 f1_d2 f1_d3 g0 g0_d1 g0_d11 g0_d12 g0_d2 g1 g1_d1 g1_d11 g1_d12 g1_d2 t y0 y1 th) ![v0, v1] 0 ∧
    Gen.adj_gp_i_diagonal_22_ng_out_0_1 g0 g0_d1 g0_d2 g1 g1_d1 g1_d2 t y0 y1 a0 a1 b bu th thu v0 v1
      = gProdY (jet_diagonal_22 f0 f0_d1 f0_d2 f0_d3 f1 f1_d1 f1_d2 f1_d3 g0 g0_d1 g0_d11 g0_d12 g0_d2 g1 g1_d1 g1_d11 g1_d12 g1_d2 t y0 y1 th) ![v0, v1] 1 ∧
    Gen.adj_gp_i_diagonal_22_ng_out_0_2 g0 g0_d1 g0_d2 g1 g1_d1 g1_d2 t y0 y1 a0 a1 b bu th thu v0 v1
      = gProdA (jet_diagonal_22 f0 f0_d1 f0_d2 f0_d3 f1 f1_d1 f1_d2 f1_d3 g0 g0_d1 g0_d11 g0_d12 g0_d2 g1 g1_d1 g1_d11 g1_d12 g1_d2 t y0 y1 th) ![a0, a1] ![v0, v1] 0 ∧
    Gen.adj_gp_i_diagonal_22_ng_out_0_3 g0 g0_d1 g0_d2 g1 g1_d1 g1_d2 t y0 y1 a0 a1 b bu th thu v0 v1
      = gProdA (jet_diagonal_22 f0 f0_d1 f0_d2 f0_d3 f1 f1_d1 f1_d2 f1_d3 g0 g0_d1 g0_d11 g0_d12 g0_d2 g1 g1_d1 g1_d11 g1_d12 g1_d2 t y0 y1 th) ![a0, a1] ![v0, v1] 1 ∧
    Gen.adj_gp_i_diagonal_22_ng_out_0_4 g0 g0_d1 g0_d2 g1 g1_d1 g1_d2 t y0 y1 a0 a1 b bu th thu v0 v1
      = gProdTh (jet_diagonal_22 f0 f0_d1 f0_d2 f0_d3 f1 f1_d1 f1_d2 f1_d3 g0 g0_d1 g0_d11 g0_d12 g0_d2 g1 g1_d1 g1_d11 g1_d12 g1_d2 t y0 y1 th) ![a0, a1] ![v0, v1] 0 ∧
    Gen.adj_gp_i_diagonal_22_ng_out_0_5 g0 g0_d1 g0_d2 g1 g1_d1 g1_d2 t y0 y1 a0 a1 b bu th thu v0 v1
      = gProdTh (jet_diagonal_22 f0 f0_d1 f0_d2 f0_d3 f1 f1_d1 f1_d2 f1_d3 g0 g0_d1 g0_d11 g0_d12 g0_d2 g1 g1_d1 g1_d11 g1_d12 g1_d2 t y0 y1 th) ![a0, a1] ![v0, v1] 1 := by
  refine ⟨?_, ?_, ?_, ?_, ?_, ?_⟩ <;>
  simp [Gen.adj_gp_i_diagonal_22_ng_out_0_0, Gen.adj_gp_i_diagonal_22_ng_out_0_1, Gen.adj_gp_i_diagonal_22_ng_out_0_2, Gen.adj_gp_i_diagonal_22_ng_out_0_3, Gen.adj_gp_i_diagonal_22_ng_out_0_4, Gen.adj_gp_i_diagonal_22_ng_out_0_5, jet_diagonal_22, stratDriftY, stratDriftA, stratDriftTh, itoDriftY, itoDriftA, itoDriftTh, gProdY, gProdA, gProdTh, gdgY, gdgA, gdgTh, driftY, driftA, driftTh, diffY, diffA, diffTh, itoCorr, itoCorrY, itoCorrTh, fStrat, fStratY, fStratTh, colCorrY, colCorrA, colCorrTh, Fin.sum_univ_two, Fin.sum_univ_one, Fin.isValue, Matrix.cons_val_zero, Matrix.cons_val_one, Matrix.cons_val_fin_one, Matrix.head_cons] <;> ring

theorem adj_gp_i_diagonal_22_ng_unused_param_zero (f0 : K → K → K → K → K) (f0_d1 : K → K → K → K → K) (f0_d2 : K → K → K → K → K) (f0_d3 : K → K → K → K → K) (f1 : K → K → K → K → K) (f1_d1 : K → K → K → K → K) (f1_d2 : K → K → K → K → K) (f1_d3 : K → K → K → K → K) (g0 : K → K → K → K) (g0_d1 : K → K → K → K) (g0_d11 : K → K → K → K) (g0_d12 : K → K → K → K) (g0_d2 : K → K → K → K) (g1 : K → K → K → K) (g1_d1 : K → K → K → K) (g1_d11 : K → K → K → K) (g1_d12 : K → K → K → K) (g1_d2 : K → K → K → K) (t y0 y1 a0 a1 b bu th thu v0 v1 : K) :
    Gen.adj_gp_i_diagonal_22_ng_out_0_5 g0 g0_d1 g0_d2 g1 g1_d1 g1_d2 t y0 y1 a0 a1 b bu th thu v0 v1 = 0 := by
  simp [Gen.adj_gp_i_diagonal_22_ng_out_0_5]

theorem adj_gp_i_diagonal_22_ng_graph (f0 : K → K → K → K → K) (f0_d1 : K → K → K → K → K) (f0_d2 : K → K → K → K → K) (f0_d3 : K → K → K → K → K) (f1 : K → K → K → K → K) (f1_d1 : K → K → K → K → K) (f1_d2 : K → K → K → K → K) (f1_d3 : K → K → K → K → K) (g0 : K → K → K → K) (g0_d1 : K → K → K → K) (g0_d11 : K → K → K → K) (g0_d12 : K → K → K → K) (g0_d2 : K → K → K → K) (g1 : K → K → K → K) (g1_d1 : K → K → K → K) (g1_d11 : K → K → K → K) (g1_d12 : K → K → K → K) (g1_d2 : K → K → K → K) (t y0 y1 a0 a1 b bu th thu v0 v1 : K) :
    Gen.adj_gp_i_diagonal_22_ng_rg_out g0 g0_d1 g0_d2 g1 g1_d1 g1_d2 t y0 y1 a0 a1 b bu th thu v0 v1 = 0 ∧
    Gen.adj_gp_i_diagonal_22_ng_leaf_out g0 g0_d1 g0_d2 g1 g1_d1 g1_d2 t y0 y1 a0 a1 b bu th thu v0 v1 = 1 ∧
    Gen.adj_gp_i_diagonal_22_ng_rg_z_after g0 g0_d1 g0_d2 g1 g1_d1 g1_d2 t y0 y1 a0 a1 b bu th thu v0 v1 = 0 ∧
    Gen.adj_gp_i_diagonal_22_ng_leaf_z_after g0 g0_d1 g0_d2 g1 g1_d1 g1_d2 t y0 y1 a0 a1 b bu th thu v0 v1 = 1 := by
  refine ⟨?_, ?_, ?_, ?_⟩ <;> simp only [Gen.adj_gp_i_diagonal_22_ng_rg_out, Gen.adj_gp_i_diagonal_22_ng_leaf_out, Gen.adj_gp_i_diagonal_22_ng_rg_z_after, Gen.adj_gp_i_diagonal_22_ng_leaf_z_after]

theorem adj_gp_i_diagonal_22_en_spec (f0 : K → K → K → K → K) (f0_d1 : K → K → K → K → K) (f0_d2 : K → K → K → K → K) (f0_d3 : K → K → K → K → K) (f1 : K → K → K → K → K) (f1_d1 : K → K → K → K → K) (f1_d2 : K → K → K → K → K) (f1_d3 : K → K → K → K → K) (g0 : K → K → K → K) (g0_d1 : K → K → K → K) (g0_d11 : K → K → K → K) (g0_d12 : K → K → K → K) (g0_d2 : K → K → K → K) (g1 : K → K → K → K) (g1_d1 : K → K → K → K) (g1_d11 : K → K → K → K) (g1_d12 : K → K → K → K) (g1_d2 : K → K → K → K) (t y0 y1 a0 a1 b bu th thu v0 v1 : K) :
    Gen.adj_gp_i_diagonal_22_en_out_0_0 g0 g0_d1 g0_d2 g1 g1_d1 g1_d2 t y0 y1 a0 a1 b bu th thu v0 v1
      = gProdY (jet_diagonal_22 f0 f0_d1 f0_d2 f0_d3 f1 f1_d1 f1_d2 f1_d3 g0 g0_d1 g0_d11 g0_d12 g0_d2 g1 g1_d1 g1_d11 g1_d12 g1_d2 t y0 y1 th) ![v0, v1] 0 ∧
    Gen.adj_gp_i_diagonal_22_en_out_0_1 g0 g0_d1 g0_d2 g1 g1_d1 g1_d2 t y0 y1 a0 a1 b bu th thu v0 v1
      = gProdY (jet_diagonal_22 f0 f0_d1 f0_d2 f0_d3 f1 f1_d1 f1_d2 f1_d3 g0 g0_d1 g0_d11 g0_d12 g0_d2 g1 g1_d1 g1_d11 g1_d12 g1_d2 t y0 y1 th) ![v0, v1] 1 ∧
    Gen.adj_gp_i_diagonal_22_en_out_0_2 g0 g0_d1 g0_d2 g1 g1_d1 g1_d2 t y0 y1 a0 a1 b bu th thu v0 v1
      = gProdA (jet_diagonal_22 f0 f0_d1 f0_d2 f0_d3 f1 f1_d1 f1_d2 f1_d3 g0 g0_d1 g0_d11 g0_d12 g0_d2 g1 g1_d1 g1_d11 g1_d12 g1_d2 t y0 y1 th) ![a0, a1] ![v0, v1] 0 ∧
    Gen.adj_gp_i_diagonal_22_en_out_0_3 g0 g0_d1 g0_d2 g1 g1_d1 g1_d2 t y0 y1 a0 a1 b bu th thu v0 v1
      = gProdA (jet_diagonal_22 f0 f0_d1 f0_d2 f0_d3 f1 f1_d1 f1_d2 f1_d3 g0 g0_d1 g0_d11 g0_d12 g0_d2 g1 g1_d1 g1_d11 g1_d12 g1_d2 t y0 y1 th) ![a0, a1] ![v0, v1] 1 ∧
    Gen.adj_gp_i_diagonal_22_en_out_0_4 g0 g0_d1 g0_d2 g1 g1_d1 g1_d2 t y0 y1 a0 a1 b bu th thu v0 v1
      = gProdTh (jet_diagonal_22 f0 f0_d1 f0_d2 f0_d3 f1 f1_d1 f1_d2 f1_d3 g0 g0_d1 g0_d11 g0_d12 g0_d2 g1 g1_d1 g1_d11 g1_d12 g1_d2 t y0 y1 th) ![a0, a1] ![v0, v1] 0 ∧
    Gen.adj_gp_i_diagonal_22_en_out_0_5 g0 g0_d1 g0_d2 g1 g1_d1 g1_d2 t y0 y1 a0 a1 b bu th thu v0 v1
      = gProdTh (jet_diagonal_22 f0 f0_d1 f0_d2 f0_d3 f1 f1_d1 f1_d2 f1_d3 g0 g0_d1 g0_d11 g0_d12 g0_d2 g1 g1_d1 g1_d11 g1_d12 g1_d2 t y0 y1 th) ![a0, a1] ![v0, v1] 1 := by
  refine ⟨?_, ?_, ?_, ?_, ?_, ?_⟩ <;>
  simp [Gen.adj_gp_i_diagonal_22_en_out_0_0, Gen.adj_gp_i_diagonal_22_en_out_0_1, Gen.adj_gp_i_diagonal_22_en_out_0_2, Gen.adj_gp_i_diagonal_22_en_out_0_3, Gen.adj_gp_i_diagonal_22_en_out_0_4, Gen.adj_gp_i_diagonal_22_en_out_0_5, jet_diagonal_22, stratDriftY, stratDriftA, stratDriftTh, itoDriftY, itoDriftA, itoDriftTh, gProdY, gProdA, gProdTh, gdgY, gdgA, gdgTh, driftY, driftA, driftTh, diffY, diffA, diffTh, itoCorr, itoCorrY, itoCorrTh, fStrat, fStratY, fStratTh, colCorrY, colCorrA, colCorrTh, Fin.sum_univ_two, Fin.sum_univ_one, Fin.isValue, Matrix.cons_val_zero, Matrix.cons_val_one, Matrix.cons_val_fin_one, Matrix.head_cons] <;> ring

theorem adj_gp_i_diagonal_22_en_unused_param_zero (f0 : K → K → K → K → K) (f0_d1 : K → K → K → K → K) (f0_d2 : K → K → K → K → K) (f0_d3 : K → K → K → K → K) (f1 : K → K → K → K → K) (f1_d1 : K → K → K → K → K) (f1_d2 : K → K → K → K → K) (f1_d3 : K → K → K → K → K) (g0 : K → K → K → K) (g0_d1 : K → K → K → K) (g0_d11 : K → K → K → K) (g0_d12 : K → K → K → K) (g0_d2 : K → K → K → K) (g1 : K → K → K → K) (g1_d1 : K → K → K → K) (g1_d11 : K → K → K → K) (g1_d12 : K → K → K → K) (g1_d2 : K → K → K → K) (t y0 y1 a0 a1 b bu th thu v0 v1 : K) :
    Gen.adj_gp_i_diagonal_22_en_out_0_5 g0 g0_d1 g0_d2 g1 g1_d1 g1_d2 t y0 y1 a0 a1 b bu th thu v0 v1 = 0 := by
  simp [Gen.adj_gp_i_diagonal_22_en_out_0_5]

theorem adj_gp_i_diagonal_22_en_graph (f0 : K → K → K → K → K) (f0_d1 : K → K → K → K → K) (f0_d2 : K → K → K → K → K) (f0_d3 : K → K → K → K → K) (f1 : K → K → K → K → K) (f1_d1 : K → K → K → K → K) (f1_d2 : K → K → K → K → K) (f1_d3 : K → K → K → K → K) (g0 : K → K → K → K) (g0_d1 : K → K → K → K) (g0_d11 : K → K → K → K) (g0_d12 : K → K → K → K) (g0_d2 : K → K → K → K) (g1 : K → K → K → K) (g1_d1 : K → K → K → K) (g1_d11 : K → K → K → K) (g1_d12 : K → K → K → K) (g1_d2 : K → K → K → K) (t y0 y1 a0 a1 b bu th thu v0 v1 : K) :
    Gen.adj_gp_i_diagonal_22_en_rg_out g0 g0_d1 g0_d2 g1 g1_d1 g1_d2 t y0 y1 a0 a1 b bu th thu v0 v1 = 1 ∧
    Gen.adj_gp_i_diagonal_22_en_leaf_out g0 g0_d1 g0_d2 g1 g1_d1 g1_d2 t y0 y1 a0 a1 b bu th thu v0 v1 = 0 ∧
    Gen.adj_gp_i_diagonal_22_en_rg_z_after g0 g0_d1 g0_d2 g1 g1_d1 g1_d2 t y0 y1 a0 a1 b bu th thu v0 v1 = 1 ∧
    Gen.adj_gp_i_diagonal_22_en_leaf_z_after g0 g0_d1 g0_d2 g1 g1_d1 g1_d2 t y0 y1 a0 a1 b bu th thu v0 v1 = 1 := by
  refine ⟨?_, ?_, ?_, ?_⟩ <;> simp only [Gen.adj_gp_i_diagonal_22_en_rg_out, Gen.adj_gp_i_diagonal_22_en_leaf_out, Gen.adj_gp_i_diagonal_22_en_rg_z_after, Gen.adj_gp_i_diagonal_22_en_leaf_z_after]

theorem adj_fgp_i_diagonal_22_ng_unused_param_zero (f0 : K → K → K → K → K) (f0_d1 : K → K → K → K → K) (f0_d2 : K → K → K → K → K) (f0_d3 : K → K → K → K → K) (f1 : K → K → K → K → K) (f1_d1 : K → K → K → K → K) (f1_d2 : K → K → K → K → K) (f1_d3 : K → K → K → K → K) (g0 : K → K → K → K) (g0_d1 : K → K → K → K) (g0_d11 : K → K → K → K) (g0_d12 : K → K → K → K) (g0_d2 : K → K → K → K) (g1 : K → K → K → K) (g1_d1 : K → K → K → K) (g1_d11 : K → K → K → K) (g1_d12 : K → K → K → K) (g1_d2 : K → K → K → K) (t y0 y1 a0 a1 b bu th thu v0 v1 : K) :
    Gen.adj_fgp_i_diagonal_22_ng_f_0_5 f0 f0_d1 f0_d2 f0_d3 f1 f1_d1 f1_d2 f1_d3 g0 g0_d1 g0_d11 g0_d12 g0_d2 g1 g1_d1 g1_d11 g1_d12 g1_d2 t y0 y1 a0 a1 b bu th thu v0 v1 = 0 ∧
    Gen.adj_fgp_i_diagonal_22_ng_gp_0_5 f0 f0_d1 f0_d2 f0_d3 f1 f1_d1 f1_d2 f1_d3 g0 g0_d1 g0_d11 g0_d12 g0_d2 g1 g1_d1 g1_d11 g1_d12 g1_d2 t y0 y1 a0 a1 b bu th thu v0 v1 = 0 := by
  refine ⟨?_, ?_⟩ <;> simp [Gen.adj_fgp_i_diagonal_22_ng_f_0_5, Gen.adj_fgp_i_diagonal_22_ng_gp_0_5]

theorem adj_fgp_i_diagonal_22_ng_pair (f0 : K → K → K → K → K) (f0_d1 : K → K → K → K → K) (f0_d2 : K → K → K → K → K) (f0_d3 : K → K → K → K → K) (f1 : K → K → K → K → K) (f1_d1 : K → K → K → K → K) (f1_d2 : K → K → K → K → K) (f1_d3 : K → K → K → K → K) (g0 : K → K → K → K) (g0_d1 : K → K → K → K) (g0_d11 : K → K → K → K) (g0_d12 : K → K → K → K) (g0_d2 : K → K → K → K) (g1 : K → K → K → K) (g1_d1 : K → K → K → K) (g1_d11 : K → K → K → K) (g1_d12 : K → K → K → K) (g1_d2 : K → K → K → K) (t y0 y1 a0 a1 b bu th thu v0 v1 : K) :
    Gen.adj_fgp_i_diagonal_22_ng_f_0_0 f0 f0_d1 f0_d2 f0_d3 f1 f1_d1 f1_d2 f1_d3 g0 g0_d1 g0_d11 g0_d12 g0_d2 g1 g1_d1 g1_d11 g1_d12 g1_d2 t y0 y1 a0 a1 b bu th thu v0 v1
      = Gen.adj_f_i_diagonal_22_ng_out_0_0 f0 f0_d1 f0_d2 f0_d3 f1 f1_d1 f1_d2 f1_d3 g0 g0_d1 g0_d11 g0_d12 g0_d2 g1 g1_d1 g1_d11 g1_d12 g1_d2 t y0 y1 a0 a1 b bu th thu ∧
    Gen.adj_fgp_i_diagonal_22_ng_f_0_1 f0 f0_d1 f0_d2 f0_d3 f1 f1_d1 f1_d2 f1_d3 g0 g0_d1 g0_d11 g0_d12 g0_d2 g1 g1_d1 g1_d11 g1_d12 g1_d2 t y0 y1 a0 a1 b bu th thu v0 v1
      = Gen.adj_f_i_diagonal_22_ng_out_0_1 f0 f0_d1 f0_d2 f0_d3 f1 f1_d1 f1_d2 f1_d3 g0 g0_d1 g0_d11 g0_d12 g0_d2 g1 g1_d1 g1_d11 g1_d12 g1_d2 t y0 y1 a0 a1 b bu th thu ∧
    Gen.adj_fgp_i_diagonal_22_ng_f_0_2 f0 f0_d1 f0_d2 f0_d3 f1 f1_d1 f1_d2 f1_d3 g0 g0_d1 g0_d11 g0_d12 g0_d2 g1 g1_d1 g1_d11 g1_d12 g1_d2 t y0 y1 a0 a1 b bu th thu v0 v1
      = Gen.adj_f_i_diagonal_22_ng_out_0_2 f0 f0_d1 f0_d2 f0_d3 f1 f1_d1 f1_d2 f1_d3 g0 g0_d1 g0_d11 g0_d12 g0_d2 g1 g1_d1 g1_d11 g1_d12 g1_d2 t y0 y1 a0 a1 b bu th thu ∧
    Gen.adj_fgp_i_diagonal_22_ng_f_0_3 f0 f0_d1 f0_d2 f0_d3 f1 f1_d1 f1_d2 f1_d3 g0 g0_d1 g0_d11 g0_d12 g0_d2 g1 g1_d1 g1_d11 g1_d12 g1_d2 t y0 y1 a0 a1 b bu th thu v0 v1
      = Gen.adj_f_i_diagonal_22_ng_out_0_3 f0 f0_d1 f0_d2 f0_d3 f1 f1_d1 f1_d2 f1_d3 g0 g0_d1 g0_d11 g0_d12 g0_d2 g1 g1_d1 g1_d11 g1_d12 g1_d2 t y0 y1 a0 a1 b bu th thu ∧
    Gen.adj_fgp_i_diagonal_22_ng_f_0_4 f0 f0_d1 f0_d2 f0_d3 f1 f1_d1 f1_d2 f1_d3 g0 g0_d1 g0_d11 g0_d12 g0_d2 g1 g1_d1 g1_d11 g1_d12 g1_d2 t y0 y1 a0 a1 b bu th thu v0 v1
      = Gen.adj_f_i_diagonal_22_ng_out_0_4 f0 f0_d1 f0_d2 f0_d3 f1 f1_d1 f1_d2 f1_d3 g0 g0_d1 g0_d11 g0_d12 g0_d2 g1 g1_d1 g1_d11 g1_d12 g1_d2 t y0 y1 a0 a1 b bu th thu ∧
    Gen.adj_fgp_i_diagonal_22_ng_f_0_5 f0 f0_d1 f0_d2 f0_d3 f1 f1_d1 f1_d2 f1_d3 g0 g0_d1 g0_d11 g0_d12 g0_d2 g1 g1_d1 g1_d11 g1_d12 g1_d2 t y0 y1 a0 a1 b bu th thu v0 v1
      = Gen.adj_f_i_diagonal_22_ng_out_0_5 f0 f0_d1 f0_d2 f0_d3 f1 f1_d1 f1_d2 f1_d3 g0 g0_d1 g0_d11 g0_d12 g0_d2 g1 g1_d1 g1_d11 g1_d12 g1_d2 t y0 y1 a0 a1 b bu th thu ∧
    Gen.adj_fgp_i_diagonal_22_ng_gp_0_0 f0 f0_d1 f0_d2 f0_d3 f1 f1_d1 f1_d2 f1_d3 g0 g0_d1 g0_d11 g0_d12 g0_d2 g1 g1_d1 g1_d11 g1_d12 g1_d2 t y0 y1 a0 a1 b bu th thu v0 v1
      = Gen.adj_gp_i_diagonal_22_ng_out_0_0 g0 g0_d1 g0_d2 g1 g1_d1 g1_d2 t y0 y1 a0 a1 b bu th thu v0 v1 ∧
    Gen.adj_fgp_i_diagonal_22_ng_gp_0_1 f0 f0_d1 f0_d2 f0_d3 f1 f1_d1 f1_d2 f1_d3 g0 g0_d1 g0_d11 g0_d12 g0_d2 g1 g1_d1 g1_d11 g1_d12 g1_d2 t y0 y1 a0 a1 b bu th thu v0 v1
      = Gen.adj_gp_i_diagonal_22_ng_out_0_1 g0 g0_d1 g0_d2 g1 g1_d1 g1_d2 t y0 y1 a0 a1 b bu th thu v0 v1 ∧
    Gen.adj_fgp_i_diagonal_22_ng_gp_0_2 f0 f0_d1 f0_d2 f0_d3 f1 f1_d1 f1_d2 f1_d3 g0 g0_d1 g0_d11 g0_d12 g0_d2 g1 g1_d1 g1_d11 g1_d12 g1_d2 t y0 y1 a0 a1 b bu th thu v0 v1
      = Gen.adj_gp_i_diagonal_22_ng_out_0_2 g0 g0_d1 g0_d2 g1 g1_d1 g1_d2 t y0 y1 a0 a1 b bu th thu v0 v1 ∧
    Gen.adj_fgp_i_diagonal_22_ng_gp_0_3 f0 f0_d1 f0_d2 f0_d3 f1 f1_d1 f1_d2 f1_d3 g0 g0_d1 g0_d11 g0_d12 g0_d2 g1 g1_d1 g1_d11 g1_d12 g1_d2 t y0 y1 a0 a1 b bu th thu v0 v1
      = Gen.adj_gp_i_diagonal_22_ng_out_0_3 g0 g0_d1 g0_d2 g1 g1_d1 g1_d2 t y0 y1 a0 a1 b bu th thu v0 v1 ∧
    Gen.adj_fgp_i_diagonal_22_ng_gp_0_4 f0 f0_d1 f0_d2 f0_d3 f1 f1_d1 f1_d2 f1_d3 g0 g0_d1 g0_d11 g0_d12 g0_d2 g1 g1_d1 g1_d11 g1_d12 g1_d2 t y0 y1 a0 a1 b bu th thu v0 v1
      = Gen.adj_gp_i_diagonal_22_ng_out_0_4 g0 g0_d1 g0_d2 g1 g1_d1 g1_d2 t y0 y1 a0 a1 b bu th thu v0 v1 ∧
    Gen.adj_fgp_i_diagonal_22_ng_gp_0_5 f0 f0_d1 f0_d2 f0_d3 f1 f1_d1 f1_d2 f1_d3 g0 g0_d1 g0_d11 g0_d12 g0_d2 g1 g1_d1 g1_d11 g1_d12 g1_d2 t y0 y1 a0 a1 b bu th thu v0 v1
      = Gen.adj_gp_i_diagonal_22_ng_out_0_5 g0 g0_d1 g0_d2 g1 g1_d1 g1_d2 t y0 y1 a0 a1 b bu th thu v0 v1 := by
  refine ⟨?_, ?_, ?_, ?_, ?_, ?_, ?_, ?_, ?_, ?_, ?_, ?_⟩ <;> simp only [Gen.adj_fgp_i_diagonal_22_ng_f_0_0, Gen.adj_f_i_diagonal_22_ng_out_0_0, Gen.adj_fgp_i_diagonal_22_ng_f_0_1, Gen.adj_f_i_diagonal_22_ng_out_0_1, Gen.adj_fgp_i_diagonal_22_ng_f_0_2, Gen.adj_f_i_diagonal_22_ng_out_0_2, Gen.adj_fgp_i_diagonal_22_ng_f_0_3, Gen.adj_f_i_diagonal_22_ng_out_0_3, Gen.adj_fgp_i_diagonal_22_ng_f_0_4, Gen.adj_f_i_diagonal_22_ng_out_0_4, Gen.adj_fgp_i_diagonal_22_ng_f_0_5, Gen.adj_f_i_diagonal_22_ng_out_0_5, Gen.adj_fgp_i_diagonal_22_ng_gp_0_0, Gen.adj_gp_i_diagonal_22_ng_out_0_0, Gen.adj_fgp_i_diagonal_22_ng_gp_0_1, Gen.adj_gp_i_diagonal_22_ng_out_0_1, Gen.adj_fgp_i_diagonal_22_ng_gp_0_2, Gen.adj_gp_i_diagonal_22_ng_out_0_2, Gen.adj_fgp_i_diagonal_22_ng_gp_0_3, Gen.adj_gp_i_diagonal_22_ng_out_0_3, Gen.adj_fgp_i_diagonal_22_ng_gp_0_4, Gen.adj_gp_i_diagonal_22_ng_out_0_4, Gen.adj_fgp_i_diagonal_22_ng_gp_0_5, Gen.adj_gp_i_diagonal_22_ng_out_0_5] <;> ring

theorem adj_fgp_i_diagonal_22_ng_graph (f0 : K → K → K → K → K) (f0_d1 : K → K → K → K → K) (f0_d2 : K → K → K → K → K) (f0_d3 : K → K → K → K → K) (f1 : K → K → K → K → K) (f1_d1 : K → K → K → K → K) (f1_d2 : K → K → K → K → K) (f1_d3 : K → K → K → K → K) (g0 : K → K → K → K) (g0_d1 : K → K → K → K) (g0_d11 : K → K → K → K) (g0_d12 : K → K → K → K) (g0_d2 : K → K → K → K) (g1 : K → K → K → K) (g1_d1 : K → K → K → K) (g1_d11 : K → K → K → K) (g1_d12 : K → K → K → K) (g1_d2 : K → K → K → K) (t y0 y1 a0 a1 b bu th thu v0 v1 : K) :
    Gen.adj_fgp_i_diagonal_22_ng_rg_f f0 f0_d1 f0_d2 f0_d3 f1 f1_d1 f1_d2 f1_d3 g0 g0_d1 g0_d11 g0_d12 g0_d2 g1 g1_d1 g1_d11 g1_d12 g1_d2 t y0 y1 a0 a1 b bu th thu v0 v1 = 0 ∧
    Gen.adj_fgp_i_diagonal_22_ng_leaf_f f0 f0_d1 f0_d2 f0_d3 f1 f1_d1 f1_d2 f1_d3 g0 g0_d1 g0_d11 g0_d12 g0_d2 g1 g1_d1 g1_d11 g1_d12 g1_d2 t y0 y1 a0 a1 b bu th thu v0 v1 = 1 ∧
    Gen.adj_fgp_i_diagonal_22_ng_rg_gp f0 f0_d1 f0_d2 f0_d3 f1 f1_d1 f1_d2 f1_d3 g0 g0_d1 g0_d11 g0_d12 g0_d2 g1 g1_d1 g1_d11 g1_d12 g1_d2 t y0 y1 a0 a1 b bu th thu v0 v1 = 0 ∧
    Gen.adj_fgp_i_diagonal_22_ng_leaf_gp f0 f0_d1 f0_d2 f0_d3 f1 f1_d1 f1_d2 f1_d3 g0 g0_d1 g0_d11 g0_d12 g0_d2 g1 g1_d1 g1_d11 g1_d12 g1_d2 t y0 y1 a0 a1 b bu th thu v0 v1 = 1 ∧
    Gen.adj_fgp_i_diagonal_22_ng_rg_z_after f0 f0_d1 f0_d2 f0_d3 f1 f1_d1 f1_d2 f1_d3 g0 g0_d1 g0_d11 g0_d12 g0_d2 g1 g1_d1 g1_d11 g1_d12 g1_d2 t y0 y1 a0 a1 b bu th thu v0 v1 = 0 ∧
    Gen.adj_fgp_i_diagonal_22_ng_leaf_z_after f0 f0_d1 f0_d2 f0_d3 f1 f1_d1 f1_d2 f1_d3 g0 g0_d1 g0_d11 g0_d12 g0_d2 g1 g1_d1 g1_d11 g1_d12 g1_d2 t y0 y1 a0 a1 b bu th thu v0 v1 = 1 := by
  refine ⟨?_, ?_, ?_, ?_, ?_, ?_⟩ <;> simp only [Gen.adj_fgp_i_diagonal_22_ng_rg_f, Gen.adj_fgp_i_diagonal_22_ng_leaf_f, Gen.adj_fgp_i_diagonal_22_ng_rg_gp, Gen.adj_fgp_i_diagonal_22_ng_leaf_gp, Gen.adj_fgp_i_diagonal_22_ng_rg_z_after, Gen.adj_fgp_i_diagonal_22_ng_leaf_z_after]

theorem adj_fgp_i_diagonal_22_en_unused_param_zero (f0 : K → K → K → K → K) (f0_d1 : K → K → K → K → K) (f0_d2 : K → K → K → K → K) (f0_d3 : K → K → K → K → K) (f1 : K → K → K → K → K) (f1_d1 : K → K → K → K → K) (f1_d2 : K → K → K → K → K) (f1_d3 : K → K → K → K → K) (g0 : K → K → K → K) (g0_d1 : K → K → K → K) (g0_d11 : K → K → K → K) (g0_d12 : K → K → K → K) (g0_d2 : K → K → K → K) (g1 : K → K → K → K) (g1_d1 : K → K → K → K) (g1_d11 : K → K → K → K) (g1_d12 : K → K → K → K) (g1_d2 : K → K → K → K) (t y0 y1 a0 a1 b bu th thu v0 v1 : K) :
    Gen.adj_fgp_i_diagonal_22_en_f_0_5 f0 f0_d1 f0_d2 f0_d3 f1 f1_d1 f1_d2 f1_d3 g0 g0_d1 g0_d11 g0_d12 g0_d2 g1 g1_d1 g1_d11 g1_d12 g1_d2 t y0 y1 a0 a1 b bu th thu v0 v1 = 0 ∧
    Gen.adj_fgp_i_diagonal_22_en_gp_0_5 f0 f0_d1 f0_d2 f0_d3 f1 f1_d1 f1_d2 f1_d3 g0 g0_d1 g0_d11 g0_d12 g0_d2 g1 g1_d1 g1_d11 g1_d12 g1_d2 t y0 y1 a0 a1 b bu th thu v0 v1 = 0 := by
  refine ⟨?_, ?_⟩ <;> simp [Gen.adj_fgp_i_diagonal_22_en_f_0_5, Gen.adj_fgp_i_diagonal_22_en_gp_0_5]

theorem adj_fgp_i_diagonal_22_en_pair (f0 : K → K → K → K → K) (f0_d1 : K → K → K → K → K) (f0_d2 : K → K → K → K → K) (f0_d3 : K → K → K → K → K) (f1 : K → K → K → K → K) (f1_d1 : K → K → K → K → K) (f1_d2 : K → K → K → K → K) (f1_d3 : K → K → K → K → K) (g0 : K → K → K → K) (g0_d1 : K → K → K → K) (g0_d11 : K → K → K → K) (g0_d12 : K → K → K → K) (g0_d2 : K → K → K → K) (g1 : K → K → K → K) (g1_d1 : K → K → K → K) (g1_d11 : K → K → K → K) (g1_d12 : K → K → K → K) (g1_d2 : K → K → K → K) (t y0 y1 a0 a1 b bu th thu v0 v1 : K) :
    Gen.adj_fgp_i_diagonal_22_en_f_0_0 f0 f0_d1 f0_d2 f0_d3 f1 f1_d1 f1_d2 f1_d3 g0 g0_d1 g0_d11 g0_d12 g0_d2 g1 g1_d1 g1_d11 g1_d12 g1_d2 t y0 y1 a0 a1 b bu th thu v0 v1
      = Gen.adj_f_i_diagonal_22_en_out_0_0 f0 f0_d1 f0_d2 f0_d3 f1 f1_d1 f1_d2 f1_d3 g0 g0_d1 g0_d11 g0_d12 g0_d2 g1 g1_d1 g1_d11 g1_d12 g1_d2 t y0 y1 a0 a1 b bu th thu ∧
    Gen.adj_fgp_i_diagonal_22_en_f_0_1 f0 f0_d1 f0_d2 f0_d3 f1 f1_d1 f1_d2 f1_d3 g0 g0_d1 g0_d11 g0_d12 g0_d2 g1 g1_d1 g1_d11 g1_d12 g1_d2 t y0 y1 a0 a1 b bu th thu v0 v1
      = Gen.adj_f_i_diagonal_22_en_out_0_1 f0 f0_d1 f0_d2 f0_d3 f1 f1_d1 f1_d2 f1_d3 g0 g0_d1 g0_d11 g0_d12 g0_d2 g1 g1_d1 g1_d11 g1_d12 g1_d2 t y0 y1 a0 a1 b bu th thu ∧
    Gen.adj_fgp_i_diagonal_22_en_f_0_2 f0 f0_d1 f0_d2 f0_d3 f1 f1_d1 f1_d2 f1_d3 g0 g0_d1 g0_d11 g0_d12 g0_d2 g1 g1_d1 g1_d11 g1_d12 g1_d2 t y0 y1 a0 a1 b bu th thu v0 v1
      = Gen.adj_f_i_diagonal_22_en_out_0_2 f0 f0_d1 f0_d2 f0_d3 f1 f1_d1 f1_d2 f1_d3 g0 g0_d1 g0_d11 g0_d12 g0_d2 g1 g1_d1 g1_d11 g1_d12 g1_d2 t y0 y1 a0 a1 b bu th thu ∧
    Gen.adj_fgp_i_diagonal_22_en_f_0_3 f0 f0_d1 f0_d2 f0_d3 f1 f1_d1 f1_d2 f1_d3 g0 g0_d1 g0_d11 g0_d12 g0_d2 g1 g1_d1 g1_d11 g1_d12 g1_d2 t y0 y1 a0 a1 b bu th thu v0 v1
      = Gen.adj_f_i_diagonal_22_en_out_0_3 f0 f0_d1 f0_d2 f0_d3 f1 f1_d1 f1_d2 f1_d3 g0 g0_d1 g0_d11 g0_d12 g0_d2 g1 g1_d1 g1_d11 g1_d12 g1_d2 t y0 y1 a0 a1 b bu th thu ∧
    Gen.adj_fgp_i_diagonal_22_en_f_0_4 f0 f0_d1 f0_d2 f0_d3 f1 f1_d1 f1_d2 f1_d3 g0 g0_d1 g0_d11 g0_d12 g0_d2 g1 g1_d1 g1_d11 g1_d12 g1_d2 t y0 y1 a0 a1 b bu th thu v0 v1
      = Gen.adj_f_i_diagonal_22_en_out_0_4 f0 f0_d1 f0_d2 f0_d3 f1 f1_d1 f1_d2 f1_d3 g0 g0_d1 g0_d11 g0_d12 g0_d2 g1 g1_d1 g1_d11 g1_d12 g1_d2 t y0 y1 a0 a1 b bu th thu ∧
    Gen.adj_fgp_i_diagonal_22_en_f_0_5 f0 f0_d1 f0_d2 f0_d3 f1 f1_d1 f1_d2 f1_d3 g0 g0_d1 g0_d11 g0_d12 g0_d2 g1 g1_d1 g1_d11 g1_d12 g1_d2 t y0 y1 a0 a1 b bu th thu v0 v1
      = Gen.adj_f_i_diagonal_22_en_out_0_5 f0 f0_d1 f0_d2 f0_d3 f1 f1_d1 f1_d2 f1_d3 g0 g0_d1 g0_d11 g0_d12 g0_d2 g1 g1_d1 g1_d11 g1_d12 g1_d2 t y0 y1 a0 a1 b bu th thu ∧
    Gen.adj_fgp_i_diagonal_22_en_gp_0_0 f0 f0_d1 f0_d2 f0_d3 f1 f1_d1 f1_d2 f1_d3 g0 g0_d1 g0_d11 g0_d12 g0_d2 g1 g1_d1 g1_d11 g1_d12 g1_d2 t y0 y1 a0 a1 b bu th thu v0 v1
      = Gen.adj_gp_i_diagonal_22_en_out_0_0 g0 g0_d1 g0_d2 g1 g1_d1 g1_d2 t y0 y1 a0 a1 b bu th thu v0 v1 ∧
    Gen.adj_fgp_i_diagonal_22_en_gp_0_1 f0 f0_d1 f0_d2 f0_d3 f1 f1_d1 f1_d2 f1_d3 g0 g0_d1 g0_d11 g0_d12 g0_d2 g1 g1_d1 g1_d11 g1_d12 g1_d2 t y0 y1 a0 a1 b bu th thu v0 v1
      = Gen.adj_gp_i_diagonal_22_en_out_0_1 g0 g0_d1 g0_d2 g1 g1_d1 g1_d2 t y0 y1 a0 a1 b bu th thu v0 v1 ∧
    Gen.adj_fgp_i_diagonal_22_en_gp_0_2 f0 f0_d1 f0_d2 f0_d3 f1 f1_d1 f1_d2 f1_d3 g0 g0_d1 g0_d11 g0_d12 g0_d2 g1 g1_d1 g1_d11 g1_d12 g1_d2 t y0 y1 a0 a1 b bu th thu v0 v1
      = Gen.adj_gp_i_diagonal_22_en_out_0_2 g0 g0_d1 g0_d2 g1 g1_d1 g1_d2 t y0 y1 a0 a1 b bu th thu v0 v1 ∧
    Gen.adj_fgp_i_diagonal_22_en_gp_0_3 f0 f0_d1 f0_d2 f0_d3 f1 f1_d1 f1_d2 f1_d3 g0 g0_d1 g0_d11 g0_d12 g0_d2 g1 g1_d1 g1_d11 g1_d12 g1_d2 t y0 y1 a0 a1 b bu th thu v0 v1
      = Gen.adj_gp_i_diagonal_22_en_out_0_3 g0 g0_d1 g0_d2 g1 g1_d1 g1_d2 t y0 y1 a0 a1 b bu th thu v0 v1 ∧
    Gen.adj_fgp_i_diagonal_22_en_gp_0_4 f0 f0_d1 f0_d2 f0_d3 f1 f1_d1 f1_d2 f1_d3 g0 g0_d1 g0_d11 g0_d12 g0_d2 g1 g1_d1 g1_d11 g1_d12 g1_d2 t y0 y1 a0 a1 b bu th thu v0 v1
      = Gen.adj_gp_i_diagonal_22_en_out_0_4 g0 g0_d1 g0_d2 g1 g1_d1 g1_d2 t y0 y1 a0 a1 b bu th thu v0 v1 ∧
    Gen.adj_fgp_i_diagonal_22_en_gp_0_5 f0 f0_d1 f0_d2 f0_d3 f1 f1_d1 f1_d2 f1_d3 g0 g0_d1 g0_d11 g0_d12 g0_d2 g1 g1_d1 g1_d11 g1_d12 g1_d2 t y0 y1 a0 a1 b bu th thu v0 v1
      = Gen.adj_gp_i_diagonal_22_en_out_0_5 g0 g0_d1 g0_d2 g1 g1_d1 g1_d2 t y0 y1 a0 a1 b bu th thu v0 v1 := by
  refine ⟨?_, ?_, ?_, ?_, ?_, ?_, ?_, ?_, ?_, ?_, ?_, ?_⟩ <;> simp only [Gen.adj_fgp_i_diagonal_22_en_f_0_0, Gen.adj_f_i_diagonal_22_en_out_0_0, Gen.adj_fgp_i_diagonal_22_en_f_0_1, Gen.adj_f_i_diagonal_22_en_out_0_1, Gen.adj_fgp_i_diagonal_22_en_f_0_2, Gen.adj_f_i_diagonal_22_en_out_0_2, Gen.adj_fgp_i_diagonal_22_en_f_0_3, Gen.adj_f_i_diagonal_22_en_out_0_3, Gen.adj_fgp_i_diagonal_22_en_f_0_4, Gen.adj_f_i_diagonal_22_en_out_0_4, Gen.adj_fgp_i_diagonal_22_en_f_0_5, Gen.adj_f_i_diagonal_22_en_out_0_5, Gen.adj_fgp_i_diagonal_22_en_gp_0_0, Gen.adj_gp_i_diagonal_22_en_out_0_0, Gen.adj_fgp_i_diagonal_22_en_gp_0_1, Gen.adj_gp_i_diagonal_22_en_out_0_1, Gen.adj_fgp_i_diagonal_22_en_gp_0_2, Gen.adj_gp_i_diagonal_22_en_out_0_2, Gen.adj_fgp_i_diagonal_22_en_gp_0_3, Gen.adj_gp_i_diagonal_22_en_out_0_3, Gen.adj_fgp_i_diagonal_22_en_gp_0_4, Gen.adj_gp_i_diagonal_22_en_out_0_4, Gen.adj_fgp_i_diagonal_22_en_gp_0_5, Gen.adj_gp_i_diagonal_22_en_out_0_5] <;> ring

theorem adj_fgp_i_diagonal_22_en_graph (f0 : K → K → K → K → K) (f0_d1 : K → K → K → K → K) (f0_d2 : K → K → K → K → K) (f0_d3 : K → K → K → K → K) (f1 : K → K → K → K → K) (f1_d1 : K → K → K → K → K) (f1_d2 : K → K → K → K → K) (f1_d3 : K → K → K → K → K) (g0 : K → K → K → K) (g0_d1 : K → K → K → K) (g0_d11 : K → K → K → K) (g0_d12 : K → K → K → K) (g0_d2 : K → K → K → K) (g1 : K → K → K → K) (g1_d1 : K → K → K → K) (g1_d11 : K → K → K → K) (g1_d12 : K → K → K → K) (g1_d2 : K → K → K → K) (t y0 y1 a0 a1 b bu th thu v0 v1 : K) :
    Gen.adj_fgp_i_diagonal_22_en_rg_f f0 f0_d1 f0_d2 f0_d3 f1 f1_d1 f1_d2 f1_d3 g0 g0_d1 g0_d11 g0_d12 g0_d2 g1 g1_d1 g1_d11 g1_d12 g1_d2 t y0 y1 a0 a1 b bu th thu v0 v1 = 1 ∧
    Gen.adj_fgp_i_diagonal_22_en_leaf_f f0 f0_d1 f0_d2 f0_d3 f1 f1_d1 f1_d2 f1_d3 g0 g0_d1 g0_d11 g0_d12 g0_d2 g1 g1_d1 g1_d11 g1_d12 g1_d2 t y0 y1 a0 a1 b bu th thu v0 v1 = 0 ∧
    Gen.adj_fgp_i_diagonal_22_en_rg_gp f0 f0_d1 f0_d2 f0_d3 f1 f1_d1 f1_d2 f1_d3 g0 g0_d1 g0_d11 g0_d12 g0_d2 g1 g1_d1 g1_d11 g1_d12 g1_d2 t y0 y1 a0 a1 b bu th thu v0 v1 = 1 ∧
    Gen.adj_fgp_i_diagonal_22_en_leaf_gp f0 f0_d1 f0_d2 f0_d3 f1 f1_d1 f1_d2 f1_d3 g0 g0_d1 g0_d11 g0_d12 g0_d2 g1 g1_d1 g1_d11 g1_d12 g1_d2 t y0 y1 a0 a1 b bu th thu v0 v1 = 0 ∧
    Gen.adj_fgp_i_diagonal_22_en_rg_z_after f0 f0_d1 f0_d2 f0_d3 f1 f1_d1 f1_d2 f1_d3 g0 g0_d1 g0_d11 g0_d12 g0_d2 g1 g1_d1 g1_d11 g1_d12 g1_d2 t y0 y1 a0 a1 b bu th thu v0 v1 = 1 ∧
    Gen.adj_fgp_i_diagonal_22_en_leaf_z_after f0 f0_d1 f0_d2 f0_d3 f1 f1_d1 f1_d2 f1_d3 g0 g0_d1 g0_d11 g0_d12 g0_d2 g1 g1_d1 g1_d11 g1_d12 g1_d2 t y0 y1 a0 a1 b bu th thu v0 v1 = 1 := by
  refine ⟨?_, ?_, ?_, ?_, ?_, ?_⟩ <;> simp only [Gen.adj_fgp_i_diagonal_22_en_rg_f, Gen.adj_fgp_i_diagonal_22_en_leaf_f, Gen.adj_fgp_i_diagonal_22_en_rg_gp, Gen.adj_fgp_i_diagonal_22_en_leaf_gp, Gen.adj_fgp_i_diagonal_22_en_rg_z_after, Gen.adj_fgp_i_diagonal_22_en_leaf_z_after]

theorem adj_gdg_i_diagonal_22_ng_spec (f0 : K → K → K → K → K) (f0_d1 : K → K → K → K → K) (f0_d2 : K → K → K → K → K) (f0_d3 : K → K → K → K → K) (f1 : K → K → K → K → K) (f1_d1 : K → K → K → K → K) (f1_d2 : K → K → K → K → K) (f1_d3 : K → K → K → K → K) (g0 : K → K → K → K) (g0_d1 : K → K → K → K) (g0_d11 : K → K → K → K) (g0_d12 : K → K → K → K) (g0_d2 : K → K → K → K) (g1 : K → K → K → K) (g1_d1 : K → K → K → K) (g1_d11 : K → K → K → K) (g1_d12 : K → K → K → K) (g1_d2 : K → K → K → K) (t y0 y1 a0 a1 b bu th thu w0 w1 v0 v1 : K) :
    Gen.adj_gdg_i_diagonal_22_ng_gp_0_0 g0 g0_d1 g0_d11 g0_d12 g0_d2 g1 g1_d1 g1_d11 g1_d12 g1_d2 t y0 y1 a0 a1 b bu th thu w0 w1 v0 v1
      = gProdY (jet_diagonal_22 f0 f0_d1 f0_d2 f0_d3 f1 f1_d1 f1_d2 f1_d3 g0 g0_d1 g0_d11 g0_d12 g0_d2 g1 g1_d1 g1_d11 g1_d12 g1_d2 t y0 y1 th) ![w0, w1] 0 ∧
    Gen.adj_gdg_i_diagonal_22_ng_gp_0_1 g0 g0_d1 g0_d11 g0_d12 g0_d2 g1 g1_d1 g1_d11 g1_d12 g1_d2 t y0 y1 a0 a1 b bu th thu w0 w1 v0 v1
      = gProdY (jet_diagonal_22 f0 f0_d1 f0_d2 f0_d3 f1 f1_d1 f1_d2 f1_d3 g0 g0_d1 g0_d11 g0_d12 g0_d2 g1 g1_d1 g1_d11 g1_d12 g1_d2 t y0 y1 th) ![w0, w1] 1 ∧
    Gen.adj_gdg_i_diagonal_22_ng_gp_0_2 g0 g0_d1 g0_d11 g0_d12 g0_d2 g1 g1_d1 g1_d11 g1_d12 g1_d2 t y0 y1 a0 a1 b bu th thu w0 w1 v0 v1
      = gProdA (jet_diagonal_22 f0 f0_d1 f0_d2 f0_d3 f1 f1_d1 f1_d2 f1_d3 g0 g0_d1 g0_d11 g0_d12 g0_d2 g1 g1_d1 g1_d11 g1_d12 g1_d2 t y0 y1 th) ![a0, a1] ![w0, w1] 0 ∧
    Gen.adj_gdg_i_diagonal_22_ng_gp_0_3 g0 g0_d1 g0_d11 g0_d12 g0_d2 g1 g1_d1 g1_d11 g1_d12 g1_d2 t y0 y1 a0 a1 b bu th thu w0 w1 v0 v1
      = gProdA (jet_diagonal_22 f0 f0_d1 f0_d2 f0_d3 f1 f1_d1 f1_d2 f1_d3 g0 g0_d1 g0_d11 g0_d12 g0_d2 g1 g1_d1 g1_d11 g1_d12 g1_d2 t y0 y1 th) ![a0, a1] ![w0, w1] 1 ∧
    Gen.adj_gdg_i_diagonal_22_ng_gp_0_4 g0 g0_d1 g0_d11 g0_d12 g0_d2 g1 g1_d1 g1_d11 g1_d12 g1_d2 t y0 y1 a0 a1 b bu th thu w0 w1 v0 v1
      = gProdTh (jet_diagonal_22 f0 f0_d1 f0_d2 f0_d3 f1 f1_d1 f1_d2 f1_d3 g0 g0_d1 g0_d11 g0_d12 g0_d2 g1 g1_d1 g1_d11 g1_d12 g1_d2 t y0 y1 th) ![a0, a1] ![w0, w1] 0 ∧
    Gen.adj_gdg_i_diagonal_22_ng_gp_0_5 g0 g0_d1 g0_d11 g0_d12 g0_d2 g1 g1_d1 g1_d11 g1_d12 g1_d2 t y0 y1 a0 a1 b bu th thu w0 w1 v0 v1
      = gProdTh (jet_diagonal_22 f0 f0_d1 f0_d2 f0_d3 f1 f1_d1 f1_d2 f1_d3 g0 g0_d1 g0_d11 g0_d12 g0_d2 g1 g1_d1 g1_d11 g1_d12 g1_d2 t y0 y1 th) ![a0, a1] ![w0, w1] 1 ∧
    Gen.adj_gdg_i_diagonal_22_ng_gdg_0_0 g0 g0_d1 g0_d11 g0_d12 g0_d2 g1 g1_d1 g1_d11 g1_d12 g1_d2 t y0 y1 a0 a1 b bu th thu w0 w1 v0 v1
      = gdgY (jet_diagonal_22 f0 f0_d1 f0_d2 f0_d3 f1 f1_d1 f1_d2 f1_d3 g0 g0_d1 g0_d11 g0_d12 g0_d2 g1 g1_d1 g1_d11 g1_d12 g1_d2 t y0 y1 th) ![v0, v1] 0 ∧
    Gen.adj_gdg_i_diagonal_22_ng_gdg_0_1 g0 g0_d1 g0_d11 g0_d12 g0_d2 g1 g1_d1 g1_d11 g1_d12 g1_d2 t y0 y1 a0 a1 b bu th thu w0 w1 v0 v1
      = gdgY (jet_diagonal_22 f0 f0_d1 f0_d2 f0_d3 f1 f1_d1 f1_d2 f1_d3 g0 g0_d1 g0_d11 g0_d12 g0_d2 g1 g1_d1 g1_d11 g1_d12 g1_d2 t y0 y1 th) ![v0, v1] 1 ∧
    Gen.adj_gdg_i_diagonal_22_ng_gdg_0_2 g0 g0_d1 g0_d11 g0_d12 g0_d2 g1 g1_d1 g1_d11 g1_d12 g1_d2 t y0 y1 a0 a1 b bu th thu w0 w1 v0 v1
      = gdgA (jet_diagonal_22 f0 f0_d1 f0_d2 f0_d3 f1 f1_d1 f1_d2 f1_d3 g0 g0_d1 g0_d11 g0_d12 g0_d2 g1 g1_d1 g1_d11 g1_d12 g1_d2 t y0 y1 th) ![a0, a1] ![v0, v1] 0 ∧
    Gen.adj_gdg_i_diagonal_22_ng_gdg_0_3 g0 g0_d1 g0_d11 g0_d12 g0_d2 g1 g1_d1 g1_d11 g1_d12 g1_d2 t y0 y1 a0 a1 b bu th thu w0 w1 v0 v1
      = gdgA (jet_diagonal_22 f0 f0_d1 f0_d2 f0_d3 f1 f1_d1 f1_d2 f1_d3 g0 g0_d1 g0_d11 g0_d12 g0_d2 g1 g1_d1 g1_d11 g1_d12 g1_d2 t y0 y1 th) ![a0, a1] ![v0, v1] 1 ∧
    Gen.adj_gdg_i_diagonal_22_ng_gdg_0_4 g0 g0_d1 g0_d11 g0_d12 g0_d2 g1 g1_d1 g1_d11 g1_d12 g1_d2 t y0 y1 a0 a1 b bu th thu w0 w1 v0 v1
      = gdgTh (jet_diagonal_22 f0 f0_d1 f0_d2 f0_d3 f1 f1_d1 f1_d2 f1_d3 g0 g0_d1 g0_d11 g0_d12 g0_d2 g1 g1_d1 g1_d11 g1_d12 g1_d2 t y0 y1 th) ![a0, a1] ![v0, v1] 0 ∧
    Gen.adj_gdg_i_diagonal_22_ng_gdg_0_5 g0 g0_d1 g0_d11 g0_d12 g0_d2 g1 g1_d1 g1_d11 g1_d12 g1_d2 t y0 y1 a0 a1 b bu th thu w0 w1 v0 v1
      = gdgTh (jet_diagonal_22 f0 f0_d1 f0_d2 f0_d3 f1 f1_d1 f1_d2 f1_d3 g0 g0_d1 g0_d11 g0_d12 g0_d2 g1 g1_d1 g1_d11 g1_d12 g1_d2 t y0 y1 th) ![a0, a1] ![v0, v1] 1 := by
  refine ⟨?_, ?_, ?_, ?_, ?_, ?_, ?_, ?_, ?_, ?_, ?_, ?_⟩ <;>
  simp [Gen.adj_gdg_i_diagonal_22_ng_gp_0_0, Gen.adj_gdg_i_diagonal_22_ng_gp_0_1, Gen.adj_gdg_i_diagonal_22_ng_gp_0_2, Gen.adj_gdg_i_diagonal_22_ng_gp_0_3, Gen.adj_gdg_i_diagonal_22_ng_gp_0_4, Gen.adj_gdg_i_diagonal_22_ng_gp_0_5, Gen.adj_gdg_i_diagonal_22_ng_gdg_0_0, Gen.adj_gdg_i_diagonal_22_ng_gdg_0_1, Gen.adj_gdg_i_diagonal_22_ng_gdg_0_2, Gen.adj_gdg_i_diagonal_22_ng_gdg_0_3, Gen.adj_gdg_i_diagonal_22_ng_gdg_0_4, Gen.adj_gdg_i_diagonal_22_ng_gdg_0_5, jet_diagonal_22, stratDriftY, stratDriftA, stratDriftTh, itoDriftY, itoDriftA, itoDriftTh, gProdY, gProdA, gProdTh, gdgY, gdgA, gdgTh, driftY, driftA, driftTh, diffY, diffA, diffTh, itoCorr, itoCorrY, itoCorrTh, fStrat, fStratY, fStratTh, colCorrY, colCorrA, colCorrTh, Fin.sum_univ_two, Fin.sum_univ_one, Fin.isValue, Matrix.cons_val_zero, Matrix.cons_val_one, Matrix.cons_val_fin_one, Matrix.head_cons] <;> ring

theorem adj_gdg_i_diagonal_22_ng_unused_param_zero (f0 : K → K → K → K → K) (f0_d1 : K → K → K → K → K) (f0_d2 : K → K → K → K → K) (f0_d3 : K → K → K → K → K) (f1 : K → K → K → K → K) (f1_d1 : K → K → K → K → K) (f1_d2 : K → K → K → K → K) (f1_d3 : K → K → K → K → K) (g0 : K → K → K → K) (g0_d1 : K → K → K → K) (g0_d11 : K → K → K → K) (g0_d12 : K → K → K → K) (g0_d2 : K → K → K → K) (g1 : K → K → K → K) (g1_d1 : K → K → K → K) (g1_d11 : K → K → K → K) (g1_d12 : K → K → K → K) (g1_d2 : K → K → K → K) (t y0 y1 a0 a1 b bu th thu w0 w1 v0 v1 : K) :
    Gen.adj_gdg_i_diagonal_22_ng_gp_0_5 g0 g0_d1 g0_d11 g0_d12 g0_d2 g1 g1_d1 g1_d11 g1_d12 g1_d2 t y0 y1 a0 a1 b bu th thu w0 w1 v0 v1 = 0 ∧
    Gen.adj_gdg_i_diagonal_22_ng_gdg_0_5 g0 g0_d1 g0_d11 g0_d12 g0_d2 g1 g1_d1 g1_d11 g1_d12 g1_d2 t y0 y1 a0 a1 b bu th thu w0 w1 v0 v1 = 0 := by
  refine ⟨?_, ?_⟩ <;> simp [Gen.adj_gdg_i_diagonal_22_ng_gp_0_5, Gen.adj_gdg_i_diagonal_22_ng_gdg_0_5]

theorem adj_gdg_i_diagonal_22_ng_pair (f0 : K → K → K → K → K) (f0_d1 : K → K → K → K → K) (f0_d2 : K → K → K → K → K) (f0_d3 : K → K → K → K → K) (f1 : K → K → K → K → K) (f1_d1 : K → K → K → K → K) (f1_d2 : K → K → K → K → K) (f1_d3 : K → K → K → K → K) (g0 : K → K → K → K) (g0_d1 : K → K → K → K) (g0_d11 : K → K → K → K) (g0_d12 : K → K → K → K) (g0_d2 : K → K → K → K) (g1 : K → K → K → K) (g1_d1 : K → K → K → K) (g1_d11 : K → K → K → K) (g1_d12 : K → K → K → K) (g1_d2 : K → K → K → K) (t y0 y1 a0 a1 b bu th thu w0 w1 v0 v1 : K) :
    Gen.adj_gdg_i_diagonal_22_ng_gp_0_0 g0 g0_d1 g0_d11 g0_d12 g0_d2 g1 g1_d1 g1_d11 g1_d12 g1_d2 t y0 y1 a0 a1 b bu th thu w0 w1 v0 v1
      = Gen.adj_gp_i_diagonal_22_ng_out_0_0 g0 g0_d1 g0_d2 g1 g1_d1 g1_d2 t y0 y1 a0 a1 b bu th thu w0 w1 ∧
    Gen.adj_gdg_i_diagonal_22_ng_gp_0_1 g0 g0_d1 g0_d11 g0_d12 g0_d2 g1 g1_d1 g1_d11 g1_d12 g1_d2 t y0 y1 a0 a1 b bu th thu w0 w1 v0 v1
      = Gen.adj_gp_i_diagonal_22_ng_out_0_1 g0 g0_d1 g0_d2 g1 g1_d1 g1_d2 t y0 y1 a0 a1 b bu th thu w0 w1 ∧
    Gen.adj_gdg_i_diagonal_22_ng_gp_0_2 g0 g0_d1 g0_d11 g0_d12 g0_d2 g1 g1_d1 g1_d11 g1_d12 g1_d2 t y0 y1 a0 a1 b bu th thu w0 w1 v0 v1
      = Gen.adj_gp_i_diagonal_22_ng_out_0_2 g0 g0_d1 g0_d2 g1 g1_d1 g1_d2 t y0 y1 a0 a1 b bu th thu w0 w1 ∧
    Gen.adj_gdg_i_diagonal_22_ng_gp_0_3 g0 g0_d1 g0_d11 g0_d12 g0_d2 g1 g1_d1 g1_d11 g1_d12 g1_d2 t y0 y1 a0 a1 b bu th thu w0 w1 v0 v1
      = Gen.adj_gp_i_diagonal_22_ng_out_0_3 g0 g0_d1 g0_d2 g1 g1_d1 g1_d2 t y0 y1 a0 a1 b bu th thu w0 w1 ∧
    Gen.adj_gdg_i_diagonal_22_ng_gp_0_4 g0 g0_d1 g0_d11 g0_d12 g0_d2 g1 g1_d1 g1_d11 g1_d12 g1_d2 t y0 y1 a0 a1 b bu th thu w0 w1 v0 v1
      = Gen.adj_gp_i_diagonal_22_ng_out_0_4 g0 g0_d1 g0_d2 g1 g1_d1 g1_d2 t y0 y1 a0 a1 b bu th thu w0 w1 ∧
    Gen.adj_gdg_i_diagonal_22_ng_gp_0_5 g0 g0_d1 g0_d11 g0_d12 g0_d2 g1 g1_d1 g1_d11 g1_d12 g1_d2 t y0 y1 a0 a1 b bu th thu w0 w1 v0 v1
      = Gen.adj_gp_i_diagonal_22_ng_out_0_5 g0 g0_d1 g0_d2 g1 g1_d1 g1_d2 t y0 y1 a0 a1 b bu th thu w0 w1 := by
  refine ⟨?_, ?_, ?_, ?_, ?_, ?_⟩ <;> simp only [Gen.adj_gdg_i_diagonal_22_ng_gp_0_0, Gen.adj_gp_i_diagonal_22_ng_out_0_0, Gen.adj_gdg_i_diagonal_22_ng_gp_0_1, Gen.adj_gp_i_diagonal_22_ng_out_0_1, Gen.adj_gdg_i_diagonal_22_ng_gp_0_2, Gen.adj_gp_i_diagonal_22_ng_out_0_2, Gen.adj_gdg_i_diagonal_22_ng_gp_0_3, Gen.adj_gp_i_diagonal_22_ng_out_0_3, Gen.adj_gdg_i_diagonal_22_ng_gp_0_4, Gen.adj_gp_i_diagonal_22_ng_out_0_4, Gen.adj_gdg_i_diagonal_22_ng_gp_0_5, Gen.adj_gp_i_diagonal_22_ng_out_0_5] <;> ring

theorem adj_gdg_i_diagonal_22_ng_graph (f0 : K → K → K → K → K) (f0_d1 : K → K → K → K → K) (f0_d2 : K → K → K → K → K) (f0_d3 : K → K → K → K → K) (f1 : K → K → K → K → K) (f1_d1 : K → K → K → K → K) (f1_d2 : K → K → K → K → K) (f1_d3 : K → K → K → K → K) (g0 : K → K → K → K) (g0_d1 : K → K → K → K) (g0_d11 : K → K → K → K) (g0_d12 : K → K → K → K) (g0_d2 : K → K → K → K) (g1 : K → K → K → K) (g1_d1 : K → K → K → K) (g1_d11 : K → K → K → K) (g1_d12 : K → K → K → K) (g1_d2 : K → K → K → K) (t y0 y1 a0 a1 b bu th thu w0 w1 v0 v1 : K) :
    Gen.adj_gdg_i_diagonal_22_ng_rg_gp g0 g0_d1 g0_d11 g0_d12 g0_d2 g1 g1_d1 g1_d11 g1_d12 g1_d2 t y0 y1 a0 a1 b bu th thu w0 w1 v0 v1 = 0 ∧
    Gen.adj_gdg_i_diagonal_22_ng_leaf_gp g0 g0_d1 g0_d11 g0_d12 g0_d2 g1 g1_d1 g1_d11 g1_d12 g1_d2 t y0 y1 a0 a1 b bu th thu w0 w1 v0 v1 = 1 ∧
    Gen.adj_gdg_i_diagonal_22_ng_rg_gdg g0 g0_d1 g0_d11 g0_d12 g0_d2 g1 g1_d1 g1_d11 g1_d12 g1_d2 t y0 y1 a0 a1 b bu th thu w0 w1 v0 v1 = 0 ∧
    Gen.adj_gdg_i_diagonal_22_ng_leaf_gdg g0 g0_d1 g0_d11 g0_d12 g0_d2 g1 g1_d1 g1_d11 g1_d12 g1_d2 t y0 y1 a0 a1 b bu th thu w0 w1 v0 v1 = 1 ∧
    Gen.adj_gdg_i_diagonal_22_ng_rg_z_after g0 g0_d1 g0_d11 g0_d12 g0_d2 g1 g1_d1 g1_d11 g1_d12 g1_d2 t y0 y1 a0 a1 b bu th thu w0 w1 v0 v1 = 0 ∧
    Gen.adj_gdg_i_diagonal_22_ng_leaf_z_after g0 g0_d1 g0_d11 g0_d12 g0_d2 g1 g1_d1 g1_d11 g1_d12 g1_d2 t y0 y1 a0 a1 b bu th thu w0 w1 v0 v1 = 1 := by
  refine ⟨?_, ?_, ?_, ?_, ?_, ?_⟩ <;> simp only [Gen.adj_gdg_i_diagonal_22_ng_rg_gp, Gen.adj_gdg_i_diagonal_22_ng_leaf_gp, Gen.adj_gdg_i_diagonal_22_ng_rg_gdg, Gen.adj_gdg_i_diagonal_22_ng_leaf_gdg, Gen.adj_gdg_i_diagonal_22_ng_rg_z_after, Gen.adj_gdg_i_diagonal_22_ng_leaf_z_after]

theorem adj_gdg_i_diagonal_22_en_spec (f0 : K → K → K → K → K) (f0_d1 : K → K → K → K → K) (f0_d2 : K → K → K → K → K) (f0_d3 : K → K → K → K → K) (f1 : K → K → K → K → K) (f1_d1 : K → K → K → K → K) (f1_d2 : K → K → K → K → K) (f1_d3 : K → K → K → K → K) (g0 : K → K → K → K) (g0_d1 : K → K → K → K) (g0_d11 : K → K → K → K) (g0_d12 : K → K → K → K) (g0_d2 : K → K → K → K) (g1 : K → K → K → K) (g1_d1 : K → K → K → K) (g1_d11 : K → K → K → K) (g1_d12 : K → K → K → K) (g1_d2 : K → K → K → K) (t y0 y1 a0 a1 b bu th thu w0 w1 v0 v1 : K) :
    Gen.adj_gdg_i_diagonal_22_en_gp_0_0 g0 g0_d1 g0_d11 g0_d12 g0_d2 g1 g1_d1 g1_d11 g1_d12 g1_d2 t y0 y1 a0 a1 b bu th thu w0 w1 v0 v1
      = gProdY (jet_diagonal_22 f0 f0_d1 f0_d2 f0_d3 f1 f1_d1 f1_d2 f1_d3 g0 g0_d1 g0_d11 g0_d12 g0_d2 g1 g1_d1 g1_d11 g1_d12 g1_d2 t y0 y1 th) ![w0, w1] 0 ∧
    Gen.adj_gdg_i_diagonal_22_en_gp_0_1 g0 g0_d1 g0_d11 g0_d12 g0_d2 g1 g1_d1 g1_d11 g1_d12 g1_d2 t y0 y1 a0 a1 b bu th thu w0 w1 v0 v1
      = gProdY (jet_diagonal_22 f0 f0_d1 f0_d2 f0_d3 f1 f1_d1 f1_d2 f1_d3 g0 g0_d1 g0_d11 g0_d12 g0_d2 g1 g1_d1 g1_d11 g1_d12 g1_d2 t y0 y1 th) ![w0, w1] 1 ∧
    Gen.adj_gdg_i_diagonal_22_en_gp_0_2 g0 g0_d1 g0_d11 g0_d12 g0_d2 g1 g1_d1 g1_d11 g1_d12 g1_d2 t y0 y1 a0 a1 b bu th thu w0 w1 v0 v1
      = gProdA (jet_diagonal_22 f0 f0_d1 f0_d2 f0_d3 f1 f1_d1 f1_d2 f1_d3 g0 g0_d1 g0_d11 g0_d12 g0_d2 g1 g1_d1 g1_d11 g1_d12 g1_d2 t y0 y1 th) ![a0, a1] ![w0, w1] 0 ∧
    Gen.adj_gdg_i_diagonal_22_en_gp_0_3 g0 g0_d1 g0_d11 g0_d12 g0_d2 g1 g1_d1 g1_d11 g1_d12 g1_d2 t y0 y1 a0 a1 b bu th thu w0 w1 v0 v1
      = gProdA (jet_diagonal_22 f0 f0_d1 f0_d2 f0_d3 f1 f1_d1 f1_d2 f1_d3 g0 g0_d1 g0_d11 g0_d12 g0_d2 g1 g1_d1 g1_d11 g1_d12 g1_d2 t y0 y1 th) ![a0, a1] ![w0, w1] 1 ∧
    Gen.adj_gdg_i_diagonal_22_en_gp_0_4 g0 g0_d1 g0_d11 g0_d12 g0_d2 g1 g1_d1 g1_d11 g1_d12 g1_d2 t y0 y1 a0 a1 b bu th thu w0 w1 v0 v1
      = gProdTh (jet_diagonal_22 f0 f0_d1 f0_d2 f0_d3 f1 f1_d1 f1_d2 f1_d3 g0 g0_d1 g0_d11 g0_d12 g0_d2 g1 g1_d1 g1_d11 g1_d12 g1_d2 t y0 y1 th) ![a0, a1] ![w0, w1] 0 ∧
    Gen.adj_gdg_i_diagonal_22_en_gp_0_5 g0 g0_d1 g0_d11 g0_d12 g0_d2 g1 g1_d1 g1_d11 g1_d12 g1_d2 t y0 y1 a0 a1 b bu th thu w0 w1 v0 v1
      = gProdTh (jet_diagonal_22 f0 f0_d1 f0_d2 f0_d3 f1 f1_d1 f1_d2 f1_d3 g0 g0_d1 g0_d11 g0_d12 g0_d2 g1 g1_d1 g1_d11 g1_d12 g1_d2 t y0 y1 th) ![a0, a1] ![w0, w1] 1 ∧
    Gen.adj_gdg_i_diagonal_22_en_gdg_0_0 g0 g0_d1 g0_d11 g0_d12 g0_d2 g1 g1_d1 g1_d11 g1_d12 g1_d2 t y0 y1 a0 a1 b bu th thu w0 w1 v0 v1
      = gdgY (jet_diagonal_22 f0 f0_d1 f0_d2 f0_d3 f1 f1_d1 f1_d2 f1_d3 g0 g0_d1 g0_d11 g0_d12 g0_d2 g1 g1_d1 g1_d11 g1_d12 g1_d2 t y0 y1 th) ![v0, v1] 0 ∧
    Gen.adj_gdg_i_diagonal_22_en_gdg_0_1 g0 g0_d1 g0_d11 g0_d12 g0_d2 g1 g1_d1 g1_d11 g1_d12 g1_d2 t y0 y1 a0 a1 b bu th thu w0 w1 v0 v1
      = gdgY (jet_diagonal_22 f0 f0_d1 f0_d2 f0_d3 f1 f1_d1 f1_d2 f1_d3 g0 g0_d1 g0_d11 g0_d12 g0_d2 g1 g1_d1 g1_d11 g1_d12 g1_d2 t y0 y1 th) ![v0, v1] 1 ∧
    Gen.adj_gdg_i_diagonal_22_en_gdg_0_2 g0 g0_d1 g0_d11 g0_d12 g0_d2 g1 g1_d1 g1_d11 g1_d12 g1_d2 t y0 y1 a0 a1 b bu th thu w0 w1 v0 v1
      = gdgA (jet_diagonal_22 f0 f0_d1 f0_d2 f0_d3 f1 f1_d1 f1_d2 f1_d3 g0 g0_d1 g0_d11 g0_d12 g0_d2 g1 g1_d1 g1_d11 g1_d12 g1_d2 t y0 y1 th) ![a0, a1] ![v0, v1] 0 ∧
    Gen.adj_gdg_i_diagonal_22_en_gdg_0_3 g0 g0_d1 g0_d11 g0_d12 g0_d2 g1 g1_d1 g1_d11 g1_d12 g1_d2 t y0 y1 a0 a1 b bu th thu w0 w1 v0 v1
      = gdgA (jet_diagonal_22 f0 f0_d1 f0_d2 f0_d3 f1 f1_d1 f1_d2 f1_d3 g0 g0_d1 g0_d11 g0_d12 g0_d2 g1 g1_d1 g1_d11 g1_d12 g1_d2 t y0 y1 th) ![a0, a1] ![v0, v1] 1 ∧
    Gen.adj_gdg_i_diagonal_22_en_gdg_0_4 g0 g0_d1 g0_d11 g0_d12 g0_d2 g1 g1_d1 g1_d11 g1_d12 g1_d2 t y0 y1 a0 a1 b bu th thu w0 w1 v0 v1
      = gdgTh (jet_diagonal_22 f0 f0_d1 f0_d2 f0_d3 f1 f1_d1 f1_d2 f1_d3 g0 g0_d1 g0_d11 g0_d12 g0_d2 g1 g1_d1 g1_d11 g1_d12 g1_d2 t y0 y1 th) ![a0, a1] ![v0, v1] 0 ∧
    Gen.adj_gdg_i_diagonal_22_en_gdg_0_5 g0 g0_d1 g0_d11 g0_d12 g0_d2 g1 g1_d1 g1_d11 g1_d12 g1_d2 t y0 y1 a0 a1 b bu th thu w0 w1 v0 v1
      = gdgTh (jet_diagonal_22 f0 f0_d1 f0_d2 f0_d3 f1 f1_d1 f1_d2 f1_d3 g0 g0_d1 g0_d11 g0_d12 g0_d2 g1 g1_d1 g1_d11 g1_d12 g1_d2 t y0 y1 th) ![a0, a1] ![v0, v1] 1 := by
  refine ⟨?_, ?_, ?_, ?_, ?_, ?_, ?_, ?_, ?_, ?_, ?_, ?_⟩ <;>
  simp [Gen.adj_gdg_i_diagonal_22_en_gp_0_0, Gen.adj_gdg_i_diagonal_22_en_gp_0_1, Gen.adj_gdg_i_diagonal_22_en_gp_0_2, Gen.adj_gdg_i_diagonal_22_en_gp_0_3, Gen.adj_gdg_i_diagonal_22_en_gp_0_4, Gen.adj_gdg_i_diagonal_22_en_gp_0_5, Gen.adj_gdg_i_diagonal_22_en_gdg_0_0, Gen.adj_gdg_i_diagonal_22_en_gdg_0_1, Gen.adj_gdg_i_diagonal_22_en_gdg_0_2, Gen.adj_gdg_i_diagonal_22_en_gdg_0_3, Gen.adj_gdg_i_diagonal_22_en_gdg_0_4, Gen.adj_gdg_i_diagonal_22_en_gdg_0_5, jet_diagonal_22, stratDriftY, stratDriftA, stratDriftTh, itoDriftY, itoDriftA, itoDriftTh, gProdY, gProdA, gProdTh, gdgY, gdgA, gdgTh, driftY, driftA, driftTh, diffY, diffA, diffTh, itoCorr, itoCorrY, itoCorrTh, fStrat, fStratY, fStratTh, colCorrY, colCorrA, colCorrTh, Fin.sum_univ_two, Fin.sum_univ_one, Fin.isValue, Matrix.cons_val_zero, Matrix.cons_val_one, Matrix.cons_val_fin_one, Matrix.head_cons] <;> ring

theorem adj_gdg_i_diagonal_22_en_unused_param_zero (f0 : K → K → K → K → K) (f0_d1 : K → K → K → K → K) (f0_d2 : K → K → K → K → K) (f0_d3 : K → K → K → K → K) (f1 : K → K → K → K → K) (f1_d1 : K → K → K → K → K) (f1_d2 : K → K → K → K → K) (f1_d3 : K → K → K → K → K) (g0 : K → K → K → K) (g0_d1 : K → K → K → K) (g0_d11 : K → K → K → K) (g0_d12 : K → K → K → K) (g0_d2 : K → K → K → K) (g1 : K → K → K → K) (g1_d1 : K → K → K → K) (g1_d11 : K → K → K → K) (g1_d12 : K → K → K → K) (g1_d2 : K → K → K → K) (t y0 y1 a0 a1 b bu th thu w0 w1 v0 v1 : K) :
    Gen.adj_gdg_i_diagonal_22_en_gp_0_5 g0 g0_d1 g0_d11 g0_d12 g0_d2 g1 g1_d1 g1_d11 g1_d12 g1_d2 t y0 y1 a0 a1 b bu th thu w0 w1 v0 v1 = 0 ∧
    Gen.adj_gdg_i_diagonal_22_en_gdg_0_5 g0 g0_d1 g0_d11 g0_d12 g0_d2 g1 g1_d1 g1_d11 g1_d12 g1_d2 t y0 y1 a0 a1 b bu th thu w0 w1 v0 v1 = 0 := by
  refine ⟨?_, ?_⟩ <;> simp [Gen.adj_gdg_i_diagonal_22_en_gp_0_5, Gen.adj_gdg_i_diagonal_22_en_gdg_0_5]

theorem adj_gdg_i_diagonal_22_en_pair (f0 : K → K → K → K → K) (f0_d1 : K → K → K → K → K) (f0_d2 : K → K → K → K → K) (f0_d3 : K → K → K → K → K) (f1 : K → K → K → K → K) (f1_d1 : K → K → K → K → K) (f1_d2 : K → K → K → K → K) (f1_d3 : K → K → K → K → K) (g0 : K → K → K → K) (g0_d1 : K → K → K → K) (g0_d11 : K → K → K → K) (g0_d12 : K → K → K → K) (g0_d2 : K → K → K → K) (g1 : K → K → K → K) (g1_d1 : K → K → K → K) (g1_d11 : K → K → K → K) (g1_d12 : K → K → K → K) (g1_d2 : K → K → K → K) (t y0 y1 a0 a1 b bu th thu w0 w1 v0 v1 : K) :
    Gen.adj_gdg_i_diagonal_22_en_gp_0_0 g0 g0_d1 g0_d11 g0_d12 g0_d2 g1 g1_d1 g1_d11 g1_d12 g1_d2 t y0 y1 a0 a1 b bu th thu w0 w1 v0 v1
      = Gen.adj_gp_i_diagonal_22_en_out_0_0 g0 g0_d1 g0_d2 g1 g1_d1 g1_d2 t y0 y1 a0 a1 b bu th thu w0 w1 ∧
    Gen.adj_gdg_i_diagonal_22_en_gp_0_1 g0 g0_d1 g0_d11 g0_d12 g0_d2 g1 g1_d1 g1_d11 g1_d12 g1_d2 t y0 y1 a0 a1 b bu th thu w0 w1 v0 v1
      = Gen.adj_gp_i_diagonal_22_en_out_0_1 g0 g0_d1 g0_d2 g1 g1_d1 g1_d2 t y0 y1 a0 a1 b bu th thu w0 w1 ∧
    Gen.adj_gdg_i_diagonal_22_en_gp_0_2 g0 g0_d1 g0_d11 g0_d12 g0_d2 g1 g1_d1 g1_d11 g1_d12 g1_d2 t y0 y1 a0 a1 b bu th thu w0 w1 v0 v1
      = Gen.adj_gp_i_diagonal_22_en_out_0_2 g0 g0_d1 g0_d2 g1 g1_d1 g1_d2 t y0 y1 a0 a1 b bu th thu w0 w1 ∧
    Gen.adj_gdg_i_diagonal_22_en_gp_0_3 g0 g0_d1 g0_d11 g0_d12 g0_d2 g1 g1_d1 g1_d11 g1_d12 g1_d2 t y0 y1 a0 a1 b bu th thu w0 w1 v0 v1
      = Gen.adj_gp_i_diagonal_22_en_out_0_3 g0 g0_d1 g0_d2 g1 g1_d1 g1_d2 t y0 y1 a0 a1 b bu th thu w0 w1 ∧
    Gen.adj_gdg_i_diagonal_22_en_gp_0_4 g0 g0_d1 g0_d11 g0_d12 g0_d2 g1 g1_d1 g1_d11 g1_d12 g1_d2 t y0 y1 a0 a1 b bu th thu w0 w1 v0 v1
      = Gen.adj_gp_i_diagonal_22_en_out_0_4 g0 g0_d1 g0_d2 g1 g1_d1 g1_d2 t y0 y1 a0 a1 b bu th thu w0 w1 ∧
    Gen.adj_gdg_i_diagonal_22_en_gp_0_5 g0 g0_d1 g0_d11 g0_d12 g0_d2 g1 g1_d1 g1_d11 g1_d12 g1_d2 t y0 y1 a0 a1 b bu th thu w0 w1 v0 v1
      = Gen.adj_gp_i_diagonal_22_en_out_0_5 g0 g0_d1 g0_d2 g1 g1_d1 g1_d2 t y0 y1 a0 a1 b bu th thu w0 w1 := by
  refine ⟨?_, ?_, ?_, ?_, ?_, ?_⟩ <;> simp only [Gen.adj_gdg_i_diagonal_22_en_gp_0_0, Gen.adj_gp_i_diagonal_22_en_out_0_0, Gen.adj_gdg_i_diagonal_22_en_gp_0_1, Gen.adj_gp_i_diagonal_22_en_out_0_1, Gen.adj_gdg_i_diagonal_22_en_gp_0_2, Gen.adj_gp_i_diagonal_22_en_out_0_2, Gen.adj_gdg_i_diagonal_22_en_gp_0_3, Gen.adj_gp_i_diagonal_22_en_out_0_3, Gen.adj_gdg_i_diagonal_22_en_gp_0_4, Gen.adj_gp_i_diagonal_22_en_out_0_4, Gen.adj_gdg_i_diagonal_22_en_gp_0_5, Gen.adj_gp_i_diagonal_22_en_out_0_5] <;> ring

theorem adj_gdg_i_diagonal_22_en_graph (f0 : K → K → K → K → K) (f0_d1 : K → K → K → K → K) (f0_d2 : K → K → K → K → K) (f0_d3 : K → K → K → K → K) (f1 : K → K → K → K → K) (f1_d1 : K → K → K → K → K) (f1_d2 : K → K → K → K → K) (f1_d3 : K → K → K → K → K) (g0 : K → K → K → K) (g0_d1 : K → K → K → K) (g0_d11 : K → K → K → K) (g0_d12 : K → K → K → K) (g0_d2 : K → K → K → K) (g1 : K → K → K → K) (g1_d1 : K → K → K → K) (g1_d11 : K → K → K → K) (g1_d12 : K → K → K → K) (g1_d2 : K → K → K → K) (t y0 y1 a0 a1 b bu th thu w0 w1 v0 v1 : K) :
    Gen.adj_gdg_i_diagonal_22_en_rg_gp g0 g0_d1 g0_d11 g0_d12 g0_d2 g1 g1_d1 g1_d11 g1_d12 g1_d2 t y0 y1 a0 a1 b bu th thu w0 w1 v0 v1 = 1 ∧
    Gen.adj_gdg_i_diagonal_22_en_leaf_gp g0 g0_d1 g0_d11 g0_d12 g0_d2 g1 g1_d1 g1_d11 g1_d12 g1_d2 t y0 y1 a0 a1 b bu th thu w0 w1 v0 v1 = 0 ∧
    Gen.adj_gdg_i_diagonal_22_en_rg_gdg g0 g0_d1 g0_d11 g0_d12 g0_d2 g1 g1_d1 g1_d11 g1_d12 g1_d2 t y0 y1 a0 a1 b bu th thu w0 w1 v0 v1 = 1 ∧
    Gen.adj_gdg_i_diagonal_22_en_leaf_gdg g0 g0_d1 g0_d11 g0_d12 g0_d2 g1 g1_d1 g1_d11 g1_d12 g1_d2 t y0 y1 a0 a1 b bu th thu w0 w1 v0 v1 = 0 ∧
    Gen.adj_gdg_i_diagonal_22_en_rg_z_after g0 g0_d1 g0_d11 g0_d12 g0_d2 g1 g1_d1 g1_d11 g1_d12 g1_d2 t y0 y1 a0 a1 b bu th thu w0 w1 v0 v1 = 1 ∧
    Gen.adj_gdg_i_diagonal_22_en_leaf_z_after g0 g0_d1 g0_d11 g0_d12 g0_d2 g1 g1_d1 g1_d11 g1_d12 g1_d2 t y0 y1 a0 a1 b bu th thu w0 w1 v0 v1 = 1 := by
  refine ⟨?_, ?_, ?_, ?_, ?_, ?_⟩ <;> simp only [Gen.adj_gdg_i_diagonal_22_en_rg_gp, Gen.adj_gdg_i_diagonal_22_en_leaf_gp, Gen.adj_gdg_i_diagonal_22_en_rg_gdg, Gen.adj_gdg_i_diagonal_22_en_leaf_gdg, Gen.adj_gdg_i_diagonal_22_en_rg_z_after, Gen.adj_gdg_i_diagonal_22_en_leaf_z_after]

theorem adj_f_i_additive_11_ng_spec (f : K → K → K → K) (f_d1 : K → K → K → K) (f_d2 : K → K → K → K) (g : K → K → K) (g_d1 : K → K → K) (t y0 a0 b bu th thu : K) :
    Gen.adj_f_i_additive_11_ng_out_0_0 f f_d1 f_d2 t y0 a0 b bu th thu
      = itoDriftY (jet_additive_11 f f_d1 f_d2 g g_d1 t y0 th) 0 ∧
    Gen.adj_f_i_additive_11_ng_out_0_1 f f_d1 f_d2 t y0 a0 b bu th thu
      = itoDriftA (jet_additive_11 f f_d1 f_d2 g g_d1 t y0 th) ![a0] 0 ∧
    Gen.adj_f_i_additive_11_ng_out_0_2 f f_d1 f_d2 t y0 a0 b bu th thu
      = itoDriftTh (jet_additive_11 f f_d1 f_d2 g g_d1 t y0 th) ![a0] 0 ∧
    Gen.adj_f_i_additive_11_ng_out_0_3 f f_d1 f_d2 t y0 a0 b bu th thu
      = itoDriftTh (jet_additive_11 f f_d1 f_d2 g g_d1 t y0 th) ![a0] 1 := by
  refine ⟨?_, ?_, ?_, ?_⟩ <;>
  simp [Gen.adj_f_i_additive_11_ng_out_0_0, Gen.adj_f_i_additive_11_ng_out_0_1, Gen.adj_f_i_additive_11_ng_out_0_2, Gen.adj_f_i_additive_11_ng_out_0_3, jet_additive_11, stratDriftY, stratDriftA, stratDriftTh, itoDriftY, itoDriftA, itoDriftTh, gProdY, gProdA, gProdTh, gdgY, gdgA, gdgTh, driftY, driftA, driftTh, diffY, diffA, diffTh, itoCorr, itoCorrY, itoCorrTh, fStrat, fStratY, fStratTh, colCorrY, colCorrA, colCorrTh, Fin.sum_univ_two, Fin.sum_univ_one, Fin.isValue, Matrix.cons_val_zero, Matrix.cons_val_one, Matrix.cons_val_fin_one, Matrix.head_cons] <;> ring

theorem adj_f_i_additive_11_ng_unused_param_zero (f : K → K → K → K) (f_d1 : K → K → K → K) (f_d2 : K → K → K → K) (g : K → K → K) (g_d1 : K → K → K) (t y0 a0 b bu th thu : K) :
    Gen.adj_f_i_additive_11_ng_out_0_3 f f_d1 f_d2 t y0 a0 b bu th thu = 0 := by
  simp [Gen.adj_f_i_additive_11_ng_out_0_3]

theorem adj_f_i_additive_11_ng_graph (f : K → K → K → K) (f_d1 : K → K → K → K) (f_d2 : K → K → K → K) (g : K → K → K) (g_d1 : K → K → K) (t y0 a0 b bu th thu : K) :
    Gen.adj_f_i_additive_11_ng_rg_out f f_d1 f_d2 t y0 a0 b bu th thu = 0 ∧
    Gen.adj_f_i_additive_11_ng_leaf_out f f_d1 f_d2 t y0 a0 b bu th thu = 1 ∧
    Gen.adj_f_i_additive_11_ng_rg_z_after f f_d1 f_d2 t y0 a0 b bu th thu = 0 ∧
    Gen.adj_f_i_additive_11_ng_leaf_z_after f f_d1 f_d2 t y0 a0 b bu th thu = 1 := by
  refine ⟨?_, ?_, ?_, ?_⟩ <;> simp only [Gen.adj_f_i_additive_11_ng_rg_out, Gen.adj_f_i_additive_11_ng_leaf_out, Gen.adj_f_i_additive_11_ng_rg_z_after, Gen.adj_f_i_additive_11_ng_leaf_z_after]

theorem adj_f_i_additive_11_en_spec (f : K → K → K → K) (f_d1 : K → K → K → K) (f_d11 : K → K → K → K) (f_d12 : K → K → K → K) (f_d2 : K → K → K → K) (f_d22 : K → K → K → K) (g : K → K → K) (g_d1 : K → K → K) (t y0 a0 b bu th thu : K) :
    Gen.adj_f_i_additive_11_en_out_0_0 f f_d1 f_d11 f_d12 f_d2 f_d22 t y0 a0 b bu th thu
      = itoDriftY (jet_additive_11 f f_d1 f_d2 g g_d1 t y0 th) 0 ∧
    Gen.adj_f_i_additive_11_en_out_0_1 f f_d1 f_d11 f_d12 f_d2 f_d22 t y0 a0 b bu th thu
      = itoDriftA (jet_additive_11 f f_d1 f_d2 g g_d1 t y0 th) ![a0] 0 ∧
    Gen.adj_f_i_additive_11_en_out_0_2 f f_d1 f_d11 f_d12 f_d2 f_d22 t y0 a0 b bu th thu
      = itoDriftTh (jet_additive_11 f f_d1 f_d2 g g_d1 t y0 th) ![a0] 0 ∧
    Gen.adj_f_i_additive_11_en_out_0_3 f f_d1 f_d11 f_d12 f_d2 f_d22 t y0 a0 b bu th thu
      = itoDriftTh (jet_additive_11 f f_d1 f_d2 g g_d1 t y0 th) ![a0] 1 := by
  refine ⟨?_, ?_, ?_, ?_⟩ <;>
  simp [Gen.adj_f_i_additive_11_en_out_0_0, Gen.adj_f_i_additive_11_en_out_0_1, Gen.adj_f_i_additive_11_en_out_0_2, Gen.adj_f_i_additive_11_en_out_0_3, jet_additive_11, stratDriftY, stratDriftA, stratDriftTh, itoDriftY, itoDriftA, itoDriftTh, gProdY, gProdA, gProdTh, gdgY, gdgA, gdgTh, driftY, driftA, driftTh, diffY, diffA, diffTh, itoCorr, itoCorrY, itoCorrTh, fStrat, fStratY, fStratTh, colCorrY, colCorrA, colCorrTh, Fin.sum_univ_two, Fin.sum_univ_one, Fin.isValue, Matrix.cons_val_zero, Matrix.cons_val_one, Matrix.cons_val_fin_one, Matrix.head_cons] <;> ring

theorem adj_f_i_additive_11_en_unused_param_zero (f : K → K → K → K) (f_d1 : K → K → K → K) (f_d11 : K → K → K → K) (f_d12 : K → K → K → K) (f_d2 : K → K → K → K) (f_d22 : K → K → K → K) (g : K → K → K) (g_d1 : K → K → K) (t y0 a0 b bu th thu : K) :
    Gen.adj_f_i_additive_11_en_out_0_3 f f_d1 f_d11 f_d12 f_d2 f_d22 t y0 a0 b bu th thu = 0 := by
  simp [Gen.adj_f_i_additive_11_en_out_0_3]

theorem adj_f_i_additive_11_en_graph (f : K → K → K → K) (f_d1 : K → K → K → K) (f_d11 : K → K → K → K) (f_d12 : K → K → K → K) (f_d2 : K → K → K → K) (f_d22 : K → K → K → K) (g : K → K → K) (g_d1 : K → K → K) (t y0 a0 b bu th thu : K) :
    Gen.adj_f_i_additive_11_en_rg_out f f_d1 f_d11 f_d12 f_d2 f_d22 t y0 a0 b bu th thu = 1 ∧
    Gen.adj_f_i_additive_11_en_leaf_out f f_d1 f_d11 f_d12 f_d2 f_d22 t y0 a0 b bu th thu = 0 ∧
    Gen.adj_f_i_additive_11_en_rg_z_after f f_d1 f_d11 f_d12 f_d2 f_d22 t y0 a0 b bu th thu = 1 ∧
    Gen.adj_f_i_additive_11_en_leaf_z_after f f_d1 f_d11 f_d12 f_d2 f_d22 t y0 a0 b bu th thu = 1 := by
  refine ⟨?_, ?_, ?_, ?_⟩ <;> simp only [Gen.adj_f_i_additive_11_en_rg_out, Gen.adj_f_i_additive_11_en_leaf_out, Gen.adj_f_i_additive_11_en_rg_z_after, Gen.adj_f_i_additive_11_en_leaf_z_after]

theorem adj_gp_i_additive_11_ng_spec (f : K → K → K → K) (f_d1 : K → K → K → K) (f_d2 : K → K → K → K) (g : K → K → K) (g_d1 : K → K → K) (t y0 a0 b bu th thu v0 : K) :
    Gen.adj_gp_i_additive_11_ng_out_0_0 g g_d1 t y0 a0 b bu th thu v0
      = gProdY (jet_additive_11 f f_d1 f_d2 g g_d1 t y0 th) ![v0] 0 ∧
    Gen.adj_gp_i_additive_11_ng_out_0_1 g g_d1 t y0 a0 b bu th thu v0
      = gProdA (jet_additive_11 f f_d1 f_d2 g g_d1 t y0 th) ![a0] ![v0] 0 ∧
    Gen.adj_gp_i_additive_11_ng_out_0_2 g g_d1 t y0 a0 b bu th thu v0
      = gProdTh (jet_additive_11 f f_d1 f_d2 g g_d1 t y0 th) ![a0] ![v0] 0 ∧
    Gen.adj_gp_i_additive_11_ng_out_0_3 g g_d1 t y0 a0 b bu th thu v0
      = gProdTh (jet_additive_11 f f_d1 f_d2 g g_d1 t y0 th) ![a0] ![v0] 1 := by
  refine ⟨?_, ?_, ?_, ?_⟩ <;>
  simp [Gen.adj_gp_i_additive_11_ng_out_0_0, Gen.adj_gp_i_additive_11_ng_out_0_1, Gen.adj_gp_i_additive_11_ng_out_0_2, Gen.adj_gp_i_additive_11_ng_out_0_3, jet_additive_11, stratDriftY, stratDriftA, stratDriftTh, itoDriftY, itoDriftA, itoDriftTh, gProdY, gProdA, gProdTh, gdgY, gdgA, gdgTh, driftY, driftA, driftTh, diffY, diffA, diffTh, itoCorr, itoCorrY, itoCorrTh, fStrat, fStratY, fStratTh, colCorrY, colCorrA, colCorrTh, Fin.sum_univ_two, Fin.sum_univ_one, Fin.isValue, Matrix.cons_val_zero, Matrix.cons_val_one, Matrix.cons_val_fin_one, Matrix.head_cons] <;> ring

theorem adj_gp_i_additive_11_ng_unused_param_zero (f : K → K → K → K) (f_d1 : K → K → K → K) (f_d2 : K → K → K → K) (g : K → K → K) (g_d1 : K → K → K) (t y0 a0 b bu th thu v0 : K) :
    Gen.adj_gp_i_additive_11_ng_out_0_3 g g_d1 t y0 a0 b bu th thu v0 = 0 := by
  simp [Gen.adj_gp_i_additive_11_ng_out_0_3]

theorem adj_gp_i_additive_11_ng_graph (f : K → K → K → K) (f_d1 : K → K → K → K) (f_d2 : K → K → K → K) (g : K → K → K) (g_d1 : K → K → K) (t y0 a0 b bu th thu v0 : K) :
    Gen.adj_gp_i_additive_11_ng_rg_out g g_d1 t y0 a0 b bu th thu v0 = 0 ∧
    Gen.adj_gp_i_additive_11_ng_leaf_out g g_d1 t y0 a0 b bu th thu v0 = 1 ∧
    Gen.adj_gp_i_additive_11_ng_rg_z_after g g_d1 t y0 a0 b bu th thu v0 = 0 ∧
    Gen.adj_gp_i_additive_11_ng_leaf_z_after g g_d1 t y0 a0 b bu th thu v0 = 1 := by
  refine ⟨?_, ?_, ?_, ?_⟩ <;> simp only [Gen.adj_gp_i_additive_11_ng_rg_out, Gen.adj_gp_i_additive_11_ng_leaf_out, Gen.adj_gp_i_additive_11_ng_rg_z_after, Gen.adj_gp_i_additive_11_ng_leaf_z_after]

theorem adj_gp_i_additive_11_en_spec (f : K → K → K → K) (f_d1 : K → K → K → K) (f_d2 : K → K → K → K) (g : K → K → K) (g_d1 : K → K → K) (g_d11 : K → K → K) (t y0 a0 b bu th thu v0 : K) :
    Gen.adj_gp_i_additive_11_en_out_0_0 g g_d1 g_d11 t y0 a0 b bu th thu v0
      = gProdY (jet_additive_11 f f_d1 f_d2 g g_d1 t y0 th) ![v0] 0 ∧
    Gen.adj_gp_i_additive_11_en_out_0_1 g g_d1 g_d11 t y0 a0 b bu th thu v0
      = gProdA (jet_additive_11 f f_d1 f_d2 g g_d1 t y0 th) ![a0] ![v0] 0 ∧
    Gen.adj_gp_i_additive_11_en_out_0_2 g g_d1 g_d11 t y0 a0 b bu th thu v0
      = gProdTh (jet_additive_11 f f_d1 f_d2 g g_d1 t y0 th) ![a0] ![v0] 0 ∧
    Gen.adj_gp_i_additive_11_en_out_0_3 g g_d1 g_d11 t y0 a0 b bu th thu v0
      = gProdTh (jet_additive_11 f f_d1 f_d2 g g_d1 t y0 th) ![a0] ![v0] 1 := by
  refine ⟨?_, ?_, ?_, ?_⟩ <;>
  simp [Gen.adj_gp_i_additive_11_en_out_0_0, Gen.adj_gp_i_additive_11_en_out_0_1, Gen.adj_gp_i_additive_11_en_out_0_2, Gen.adj_gp_i_additive_11_en_out_0_3, jet_additive_11, stratDriftY, stratDriftA, stratDriftTh, itoDriftY, itoDriftA, itoDriftTh, gProdY, gProdA, gProdTh, gdgY, gdgA, gdgTh, driftY, driftA, driftTh, diffY, diffA, diffTh, itoCorr, itoCorrY, itoCorrTh, fStrat, fStratY, fStratTh, colCorrY, colCorrA, colCorrTh, Fin.sum_univ_two, Fin.sum_univ_one, Fin.isValue, Matrix.cons_val_zero, Matrix.cons_val_one, Matrix.cons_val_fin_one, Matrix.head_cons] <;> ring

theorem adj_gp_i_additive_11_en_unused_param_zero (f : K → K → K → K) (f_d1 : K → K → K → K) (f_d2 : K → K → K → K) (g : K → K → K) (g_d1 : K → K → K) (g_d11 : K → K → K) (t y0 a0 b bu th thu v0 : K) :
    Gen.adj_gp_i_additive_11_en_out_0_3 g g_d1 g_d11 t y0 a0 b bu th thu v0 = 0 := by
  simp [Gen.adj_gp_i_additive_11_en_out_0_3]

theorem adj_gp_i_additive_11_en_graph (f : K → K → K → K) (f_d1 : K → K → K → K) (f_d2 : K → K → K → K) (g : K → K → K) (g_d1 : K → K → K) (g_d11 : K → K → K) (t y0 a0 b bu th thu v0 : K) :
    Gen.adj_gp_i_additive_11_en_rg_out g g_d1 g_d11 t y0 a0 b bu th thu v0 = 1 ∧
    Gen.adj_gp_i_additive_11_en_leaf_out g g_d1 g_d11 t y0 a0 b bu th thu v0 = 0 ∧
    Gen.adj_gp_i_additive_11_en_rg_z_after g g_d1 g_d11 t y0 a0 b bu th thu v0 = 1 ∧
    Gen.adj_gp_i_additive_11_en_leaf_z_after g g_d1 g_d11 t y0 a0 b bu th thu v0 = 1 := by
  refine ⟨?_, ?_, ?_, ?_⟩ <;> simp only [Gen.adj_gp_i_additive_11_en_rg_out, Gen.adj_gp_i_additive_11_en_leaf_out, Gen.adj_gp_i_additive_11_en_rg_z_after, Gen.adj_gp_i_additive_11_en_leaf_z_after]

theorem adj_fgp_i_additive_11_ng_unused_param_zero (f : K → K → K → K) (f_d1 : K → K → K → K) (f_d2 : K → K → K → K) (g : K → K → K) (g_d1 : K → K → K) (t y0 a0 b bu th thu v0 : K) :
    Gen.adj_fgp_i_additive_11_ng_f_0_3 f f_d1 f_d2 g g_d1 t y0 a0 b bu th thu v0 = 0 ∧
    Gen.adj_fgp_i_additive_11_ng_gp_0_3 f f_d1 f_d2 g g_d1 t y0 a0 b bu th thu v0 = 0 := by
  refine ⟨?_, ?_⟩ <;> simp [Gen.adj_fgp_i_additive_11_ng_f_0_3, Gen.adj_fgp_i_additive_11_ng_gp_0_3]

theorem adj_fgp_i_additive_11_ng_pair (f : K → K → K → K) (f_d1 : K → K → K → K) (f_d2 : K → K → K → K) (g : K → K → K) (g_d1 : K → K → K) (t y0 a0 b bu th thu v0 : K) :
    Gen.adj_fgp_i_additive_11_ng_f_0_0 f f_d1 f_d2 g g_d1 t y0 a0 b bu th thu v0
      = Gen.adj_f_i_additive_11_ng_out_0_0 f f_d1 f_d2 t y0 a0 b bu th thu ∧
    Gen.adj_fgp_i_additive_11_ng_f_0_1 f f_d1 f_d2 g g_d1 t y0 a0 b bu th thu v0
      = Gen.adj_f_i_additive_11_ng_out_0_1 f f_d1 f_d2 t y0 a0 b bu th thu ∧
    Gen.adj_fgp_i_additive_11_ng_f_0_2 f f_d1 f_d2 g g_d1 t y0 a0 b bu th thu v0
      = Gen.adj_f_i_additive_11_ng_out_0_2 f f_d1 f_d2 t y0 a0 b bu th thu ∧
    Gen.adj_fgp_i_additive_11_ng_f_0_3 f f_d1 f_d2 g g_d1 t y0 a0 b bu th thu v0
      = Gen.adj_f_i_additive_11_ng_out_0_3 f f_d1 f_d2 t y0 a0 b bu th thu ∧
    Gen.adj_fgp_i_additive_11_ng_gp_0_0 f f_d1 f_d2 g g_d1 t y0 a0 b bu th thu v0
      = Gen.adj_gp_i_additive_11_ng_out_0_0 g g_d1 t y0 a0 b bu th thu v0 ∧
    Gen.adj_fgp_i_additive_11_ng_gp_0_1 f f_d1 f_d2 g g_d1 t y0 a0 b bu th thu v0
      = Gen.adj_gp_i_additive_11_ng_out_0_1 g g_d1 t y0 a0 b bu th thu v0 ∧
    Gen.adj_fgp_i_additive_11_ng_gp_0_2 f f_d1 f_d2 g g_d1 t y0 a0 b bu th thu v0
      = Gen.adj_gp_i_additive_11_ng_out_0_2 g g_d1 t y0 a0 b bu th thu v0 ∧
    Gen.adj_fgp_i_additive_11_ng_gp_0_3 f f_d1 f_d2 g g_d1 t y0 a0 b bu th thu v0
      = Gen.adj_gp_i_additive_11_ng_out_0_3 g g_d1 t y0 a0 b bu th thu v0 := by
  refine ⟨?_, ?_, ?_, ?_, ?_, ?_, ?_, ?_⟩ <;> simp only [Gen.adj_fgp_i_additive_11_ng_f_0_0, Gen.adj_f_i_additive_11_ng_out_0_0, Gen.adj_fgp_i_additive_11_ng_f_0_1, Gen.adj_f_i_additive_11_ng_out_0_1, Gen.adj_fgp_i_additive_11_ng_f_0_2, Gen.adj_f_i_additive_11_ng_out_0_2, Gen.adj_fgp_i_additive_11_ng_f_0_3, Gen.adj_f_i_additive_11_ng_out_0_3, Gen.adj_fgp_i_additive_11_ng_gp_0_0, Gen.adj_gp_i_additive_11_ng_out_0_0, Gen.adj_fgp_i_additive_11_ng_gp_0_1, Gen.adj_gp_i_additive_11_ng_out_0_1, Gen.adj_fgp_i_additive_11_ng_gp_0_2, Gen.adj_gp_i_additive_11_ng_out_0_2, Gen.adj_fgp_i_additive_11_ng_gp_0_3, Gen.adj_gp_i_additive_11_ng_out_0_3] <;> ring

theorem adj_fgp_i_additive_11_ng_graph (f : K → K → K → K) (f_d1 : K → K → K → K) (f_d2 : K → K → K → K) (g : K → K → K) (g_d1 : K → K → K) (t y0 a0 b bu th thu v0 : K) :
    Gen.adj_fgp_i_additive_11_ng_rg_f f f_d1 f_d2 g g_d1 t y0 a0 b bu th thu v0 = 0 ∧
    Gen.adj_fgp_i_additive_11_ng_leaf_f f f_d1 f_d2 g g_d1 t y0 a0 b bu th thu v0 = 1 ∧
    Gen.adj_fgp_i_additive_11_ng_rg_gp f f_d1 f_d2 g g_d1 t y0 a0 b bu th thu v0 = 0 ∧
    Gen.adj_fgp_i_additive_11_ng_leaf_gp f f_d1 f_d2 g g_d1 t y0 a0 b bu th thu v0 = 1 ∧
    Gen.adj_fgp_i_additive_11_ng_rg_z_after f f_d1 f_d2 g g_d1 t y0 a0 b bu th thu v0 = 0 ∧
    Gen.adj_fgp_i_additive_11_ng_leaf_z_after f f_d1 f_d2 g g_d1 t y0 a0 b bu th thu v0 = 1 := by
  refine ⟨?_, ?_, ?_, ?_, ?_, ?_⟩ <;> simp only [Gen.adj_fgp_i_additive_11_ng_rg_f, Gen.adj_fgp_i_additive_11_ng_leaf_f, Gen.adj_fgp_i_additive_11_ng_rg_gp, Gen.adj_fgp_i_additive_11_ng_leaf_gp, Gen.adj_fgp_i_additive_11_ng_rg_z_after, Gen.adj_fgp_i_additive_11_ng_leaf_z_after]

theorem adj_fgp_i_additive_11_en_unused_param_zero (f : K → K → K → K) (f_d1 : K → K → K → K) (f_d2 : K → K → K → K) (g : K → K → K) (g_d1 : K → K → K) (t y0 a0 b bu th thu v0 : K) :
    Gen.adj_fgp_i_additive_11_en_f_0_3 f f_d1 f_d2 g g_d1 t y0 a0 b bu th thu v0 = 0 ∧
    Gen.adj_fgp_i_additive_11_en_gp_0_3 f f_d1 f_d2 g g_d1 t y0 a0 b bu th thu v0 = 0 := by
  refine ⟨?_, ?_⟩ <;> simp [Gen.adj_fgp_i_additive_11_en_f_0_3, Gen.adj_fgp_i_additive_11_en_gp_0_3]

theorem adj_fgp_i_additive_11_en_pair (f : K → K → K → K) (f_d1 : K → K → K → K) (f_d2 : K → K → K → K) (g : K → K → K) (g_d1 : K → K → K) (t y0 a0 b bu th thu v0 : K) :
    Gen.adj_fgp_i_additive_11_en_f_0_0 f f_d1 f_d2 g g_d1 t y0 a0 b bu th thu v0
      = Gen.adj_f_i_additive_11_en_out_0_0 f f_d1 f_d11 f_d12 f_d2 f_d22 t y0 a0 b bu th thu ∧
    Gen.adj_fgp_i_additive_11_en_f_0_1 f f_d1 f_d2 g g_d1 t y0 a0 b bu th thu v0
      = Gen.adj_f_i_additive_11_en_out_0_1 f f_d1 f_d11 f_d12 f_d2 f_d22 t y0 a0 b bu th thu ∧
    Gen.adj_fgp_i_additive_11_en_f_0_2 f f_d1 f_d2 g g_d1 t y0 a0 b bu th thu v0
      = Gen.adj_f_i_additive_11_en_out_0_2 f f_d1 f_d11 f_d12 f_d2 f_d22 t y0 a0 b bu th thu ∧
    Gen.adj_fgp_i_additive_11_en_f_0_3 f f_d1 f_d2 g g_d1 t y0 a0 b bu th thu v0
      = Gen.adj_f_i_additive_11_en_out_0_3 f f_d1 f_d11 f_d12 f_d2 f_d22 t y0 a0 b bu th thu ∧
    Gen.adj_fgp_i_additive_11_en_gp_0_0 f f_d1 f_d2 g g_d1 t y0 a0 b bu th thu v0
      = Gen.adj_gp_i_additive_11_en_out_0_0 g g_d1 g_d11 t y0 a0 b bu th thu v0 ∧
    Gen.adj_fgp_i_additive_11_en_gp_0_1 f f_d1 f_d2 g g_d1 t y0 a0 b bu th thu v0
      = Gen.adj_gp_i_additive_11_en_out_0_1 g g_d1 g_d11 t y0 a0 b bu th thu v0 ∧
    Gen.adj_fgp_i_additive_11_en_gp_0_2 f f_d1 f_d2 g g_d1 t y0 a0 b bu th thu v0
      = Gen.adj_gp_i_additive_11_en_out_0_2 g g_d1 g_d11 t y0 a0 b bu th thu v0 ∧
    Gen.adj_fgp_i_additive_11_en_gp_0_3 f f_d1 f_d2 g g_d1 t y0 a0 b bu th thu v0
      = Gen.adj_gp_i_additive_11_en_out_0_3 g g_d1 g_d11 t y0 a0 b bu th thu v0 := by
  refine ⟨?_, ?_, ?_, ?_, ?_, ?_, ?_, ?_⟩ <;> simp only [Gen.adj_fgp_i_additive_11_en_f_0_0, Gen.adj_f_i_additive_11_en_out_0_0, Gen.adj_fgp_i_additive_11_en_f_0_1, Gen.adj_f_i_additive_11_en_out_0_1, Gen.adj_fgp_i_additive_11_en_f_0_2, Gen.adj_f_i_additive_11_en_out_0_2, Gen.adj_fgp_i_additive_11_en_f_0_3, Gen.adj_f_i_additive_11_en_out_0_3, Gen.adj_fgp_i_additive_11_en_gp_0_0, Gen.adj_gp_i_additive_11_en_out_0_0, Gen.adj_fgp_i_additive_11_en_gp_0_1, Gen.adj_gp_i_additive_11_en_out_0_1, Gen.adj_fgp_i_additive_11_en_gp_0_2, Gen.adj_gp_i_additive_11_en_out_0_2, Gen.adj_fgp_i_additive_11_en_gp_0_3, Gen.adj_gp_i_additive_11_en_out_0_3] <;> ring

theorem adj_fgp_i_additive_11_en_graph (f : K → K → K → K) (f_d1 : K → K → K → K) (f_d2 : K → K → K → K) (g : K → K → K) (g_d1 : K → K → K) (t y0 a0 b bu th thu v0 : K) :
    Gen.adj_fgp_i_additive_11_en_rg_f f f_d1 f_d2 g g_d1 t y0 a0 b bu th thu v0 = 1 ∧
    Gen.adj_fgp_i_additive_11_en_leaf_f f f_d1 f_d2 g g_d1 t y0 a0 b bu th thu v0 = 0 ∧
    Gen.adj_fgp_i_additive_11_en_rg_gp f f_d1 f_d2 g g_d1 t y0 a0 b bu th thu v0 = 1 ∧
    Gen.adj_fgp_i_additive_11_en_leaf_gp f f_d1 f_d2 g g_d1 t y0 a0 b bu th thu v0 = 0 ∧
    Gen.adj_fgp_i_additive_11_en_rg_z_after f f_d1 f_d2 g g_d1 t y0 a0 b bu th thu v0 = 1 ∧
    Gen.adj_fgp_i_additive_11_en_leaf_z_after f f_d1 f_d2 g g_d1 t y0 a0 b bu th thu v0 = 1 := by
  refine ⟨?_, ?_, ?_, ?_, ?_, ?_⟩ <;> simp only [Gen.adj_fgp_i_additive_11_en_rg_f, Gen.adj_fgp_i_additive_11_en_leaf_f, Gen.adj_fgp_i_additive_11_en_rg_gp, Gen.adj_fgp_i_additive_11_en_leaf_gp, Gen.adj_fgp_i_additive_11_en_rg_z_after, Gen.adj_fgp_i_additive_11_en_leaf_z_after]

theorem adj_f_i_scalar_11_ng_spec (f : K → K → K → K) (f_d1 : K → K → K → K) (f_d2 : K → K → K → K) (g : K → K → K → K) (g_d1 : K → K → K → K) (g_d11 : K → K → K → K) (g_d12 : K → K → K → K) (g_d2 : K → K → K → K) (t y0 a0 b bu th thu : K) :
    Gen.adj_f_i_scalar_11_ng_out_0_0 f f_d1 f_d2 g g_d1 g_d11 g_d12 g_d2 t y0 a0 b bu th thu
      = itoDriftY (jet_scalar_11 f f_d1 f_d2 g g_d1 g_d11 g_d12 g_d2 t y0 th) 0 ∧
    Gen.adj_f_i_scalar_11_ng_out_0_1 f f_d1 f_d2 g g_d1 g_d11 g_d12 g_d2 t y0 a0 b bu th thu
      = itoDriftA (jet_scalar_11 f f_d1 f_d2 g g_d1 g_d11 g_d12 g_d2 t y0 th) ![a0] 0 ∧
    Gen.adj_f_i_scalar_11_ng_out_0_2 f f_d1 f_d2 g g_d1 g_d11 g_d12 g_d2 t y0 a0 b bu th thu
      = itoDriftTh (jet_scalar_11 f f_d1 f_d2 g g_d1 g_d11 g_d12 g_d2 t y0 th) ![a0] 0 ∧
    Gen.adj_f_i_scalar_11_ng_out_0_3 f f_d1 f_d2 g g_d1 g_d11 g_d12 g_d2 t y0 a0 b bu th thu
      = itoDriftTh (jet_scalar_11 f f_d1 f_d2 g g_d1 g_d11 g_d12 g_d2 t y0 th) ![a0] 1 := by
  refine ⟨?_, ?_, ?_, ?_⟩ <;>
  simp [Gen.adj_f_i_scalar_11_ng_out_0_0, Gen.adj_f_i_scalar_11_ng_out_0_1, Gen.adj_f_i_scalar_11_ng_out_0_2, Gen.adj_f_i_scalar_11_ng_out_0_3, jet_scalar_11, stratDriftY, stratDriftA, stratDriftTh, itoDriftY, itoDriftA, itoDriftTh, gProdY, gProdA, gProdTh, gdgY, gdgA, gdgTh, driftY, driftA, driftTh, diffY, diffA, diffTh, itoCorr, itoCorrY, itoCorrTh, fStrat, fStratY, fStratTh, colCorrY, colCorrA, colCorrTh, Fin.sum_univ_two, Fin.sum_univ_one, Fin.isValue, Matrix.cons_val_zero, Matrix.cons_val_one, Matrix.cons_val_fin_one, Matrix.head_cons] <;> ring

theorem adj_f_i_scalar_11_ng_unused_param_zero (f : K → K → K → K) (f_d1 : K → K → K → K) (f_d2 : K → K → K → K) (g : K → K → K → K) (g_d1 : K → K → K → K) (g_d11 : K → K → K → K) (g_d12 : K → K → K → K) (g_d2 : K → K → K → K) (t y0 a0 b bu th thu : K) :
    Gen.adj_f_i_scalar_11_ng_out_0_3 f f_d1 f_d2 g g_d1 g_d11 g_d12 g_d2 t y0 a0 b bu th thu = 0 := by
  simp [Gen.adj_f_i_scalar_11_ng_out_0_3]

theorem adj_f_i_scalar_11_ng_graph (f : K → K → K → K) (f_d1 : K → K → K → K) (f_d2 : K → K → K → K) (g : K → K → K → K) (g_d1 : K → K → K → K) (g_d11 : K → K → K → K) (g_d12 : K → K → K → K) (g_d2 : K → K → K → K) (t y0 a0 b bu th thu : K) :
    Gen.adj_f_i_scalar_11_ng_rg_out f f_d1 f_d2 g g_d1 g_d11 g_d12 g_d2 t y0 a0 b bu th thu = 0 ∧
    Gen.adj_f_i_scalar_11_ng_leaf_out f f_d1 f_d2 g g_d1 g_d11 g_d12 g_d2 t y0 a0 b bu th thu = 1 ∧
    Gen.adj_f_i_scalar_11_ng_rg_z_after f f_d1 f_d2 g g_d1 g_d11 g_d12 g_d2 t y0 a0 b bu th thu = 0 ∧
    Gen.adj_f_i_scalar_11_ng_leaf_z_after f f_d1 f_d2 g g_d1 g_d11 g_d12 g_d2 t y0 a0 b bu th thu = 1 := by
  refine ⟨?_, ?_, ?_, ?_⟩ <;> simp only [Gen.adj_f_i_scalar_11_ng_rg_out, Gen.adj_f_i_scalar_11_ng_leaf_out, Gen.adj_f_i_scalar_11_ng_rg_z_after, Gen.adj_f_i_scalar_11_ng_leaf_z_after]

theorem adj_f_i_scalar_11_en_spec (f : K → K → K → K) (f_d1 : K → K → K → K) (f_d11 : K → K → K → K) (f_d12 : K → K → K → K) (f_d2 : K → K → K → K) (f_d22 : K → K → K → K) (g : K → K → K → K) (g_d1 : K → K → K → K) (g_d11 : K → K → K → K) (g_d111 : K → K → K → K) (g_d112 : K → K → K → K) (g_d12 : K → K → K → K) (g_d122 : K → K → K → K) (g_d2 : K → K → K → K) (g_d22 : K → K → K → K) (t y0 a0 b bu th thu : K) :
    Gen.adj_f_i_scalar_11_en_out_0_0 f f_d1 f_d11 f_d12 f_d2 f_d22 g g_d1 g_d11 g_d111 g_d112 g_d12 g_d122 g_d2 g_d22 t y0 a0 b bu th thu
      = itoDriftY (jet_scalar_11 f f_d1 f_d2 g g_d1 g_d11 g_d12 g_d2 t y0 th) 0 ∧
    Gen.adj_f_i_scalar_11_en_out_0_1 f f_d1 f_d11 f_d12 f_d2 f_d22 g g_d1 g_d11 g_d111 g_d112 g_d12 g_d122 g_d2 g_d22 t y0 a0 b bu th thu
      = itoDriftA (jet_scalar_11 f f_d1 f_d2 g g_d1 g_d11 g_d12 g_d2 t y0 th) ![a0] 0 ∧
    Gen.adj_f_i_scalar_11_en_out_0_2 f f_d1 f_d11 f_d12 f_d2 f_d22 g g_d1 g_d11 g_d111 g_d112 g_d12 g_d122 g_d2 g_d22 t y0 a0 b bu th thu
      = itoDriftTh (jet_scalar_11 f f_d1 f_d2 g g_d1 g_d11 g_d12 g_d2 t y0 th) ![a0] 0 ∧
    Gen.adj_f_i_scalar_11_en_out_0_3 f f_d1 f_d11 f_d12 f_d2 f_d22 g g_d1 g_d11 g_d111 g_d112 g_d12 g_d122 g_d2 g_d22 t y0 a0 b bu th thu
      = itoDriftTh (jet_scalar_11 f f_d1 f_d2 g g_d1 g_d11 g_d12 g_d2 t y0 th) ![a0] 1 := by
  refine ⟨?_, ?_, ?_, ?_⟩ <;>
  simp [Gen.adj_f_i_scalar_11_en_out_0_0, Gen.adj_f_i_scalar_11_en_out_0_1, Gen.adj_f_i_scalar_11_en_out_0_2, Gen.adj_f_i_scalar_11_en_out_0_3, jet_scalar_11, stratDriftY, stratDriftA, stratDriftTh, itoDriftY, itoDriftA, itoDriftTh, gProdY, gProdA, gProdTh, gdgY, gdgA, gdgTh, driftY, driftA, driftTh, diffY, diffA, diffTh, itoCorr, itoCorrY, itoCorrTh, fStrat, fStratY, fStratTh, colCorrY, colCorrA, colCorrTh, Fin.sum_univ_two, Fin.sum_univ_one, Fin.isValue, Matrix.cons_val_zero, Matrix.cons_val_one, Matrix.cons_val_fin_one, Matrix.head_cons] <;> ring

theorem adj_f_i_scalar_11_en_unused_param_zero (f : K → K → K → K) (f_d1 : K → K → K → K) (f_d11 : K → K → K → K) (f_d12 : K → K → K → K) (f_d2 : K → K → K → K) (f_d22 : K → K → K → K) (g : K → K → K → K) (g_d1 : K → K → K → K) (g_d11 : K → K → K → K) (g_d111 : K → K → K → K) (g_d112 : K → K → K → K) (g_d12 : K → K → K → K) (g_d122 : K → K → K → K) (g_d2 : K → K → K → K) (g_d22 : K → K → K → K) (t y0 a0 b bu th thu : K) :
    Gen.adj_f_i_scalar_11_en_out_0_3 f f_d1 f_d11 f_d12 f_d2 f_d22 g g_d1 g_d11 g_d111 g_d112 g_d12 g_d122 g_d2 g_d22 t y0 a0 b bu th thu = 0 := by
  simp [Gen.adj_f_i_scalar_11_en_out_0_3]

theorem adj_f_i_scalar_11_en_graph (f : K → K → K → K) (f_d1 : K → K → K → K) (f_d11 : K → K → K → K) (f_d12 : K → K → K → K) (f_d2 : K → K → K → K) (f_d22 : K → K → K → K) (g : K → K → K → K) (g_d1 : K → K → K → K) (g_d11 : K → K → K → K) (g_d111 : K → K → K → K) (g_d112 : K → K → K → K) (g_d12 : K → K → K → K) (g_d122 : K → K → K → K) (g_d2 : K → K → K → K) (g_d22 : K → K → K → K) (t y0 a0 b bu th thu : K) :
    Gen.adj_f_i_scalar_11_en_rg_out f f_d1 f_d11 f_d12 f_d2 f_d22 g g_d1 g_d11 g_d111 g_d112 g_d12 g_d122 g_d2 g_d22 t y0 a0 b bu th thu = 1 ∧
    Gen.adj_f_i_scalar_11_en_leaf_out f f_d1 f_d11 f_d12 f_d2 f_d22 g g_d1 g_d11 g_d111 g_d112 g_d12 g_d122 g_d2 g_d22 t y0 a0 b bu th thu = 0 ∧
    Gen.adj_f_i_scalar_11_en_rg_z_after f f_d1 f_d11 f_d12 f_d2 f_d22 g g_d1 g_d11 g_d111 g_d112 g_d12 g_d122 g_d2 g_d22 t y0 a0 b bu th thu = 1 ∧
    Gen.adj_f_i_scalar_11_en_leaf_z_after f f_d1 f_d11 f_d12 f_d2 f_d22 g g_d1 g_d11 g_d111 g_d112 g_d12 g_d122 g_d2 g_d22 t y0 a0 b bu th thu = 1 := by
  refine ⟨?_, ?_, ?_, ?_⟩ <;> simp only [Gen.adj_f_i_scalar_11_en_rg_out, Gen.adj_f_i_scalar_11_en_leaf_out, Gen.adj_f_i_scalar_11_en_rg_z_after, Gen.adj_f_i_scalar_11_en_leaf_z_after]

theorem adj_gp_i_scalar_11_ng_spec (f : K → K → K → K) (f_d1 : K → K → K → K) (f_d2 : K → K → K → K) (g : K → K → K → K) (g_d1 : K → K → K → K) (g_d11 : K → K → K → K) (g_d12 : K → K → K → K) (g_d2 : K → K → K → K) (t y0 a0 b bu th thu v0 : K) :
    Gen.adj_gp_i_scalar_11_ng_out_0_0 g g_d1 g_d2 t y0 a0 b bu th thu v0
      = gProdY (jet_scalar_11 f f_d1 f_d2 g g_d1 g_d11 g_d12 g_d2 t y0 th) ![v0] 0 ∧
    Gen.adj_gp_i_scalar_11_ng_out_0_1 g g_d1 g_d2 t y0 a0 b bu th thu v0
      = gProdA (jet_scalar_11 f f_d1 f_d2 g g_d1 g_d11 g_d12 g_d2 t y0 th) ![a0] ![v0] 0 ∧
    Gen.adj_gp_i_scalar_11_ng_out_0_2 g g_d1 g_d2 t y0 a0 b bu th thu v0
      = gProdTh (jet_scalar_11 f f_d1 f_d2 g g_d1 g_d11 g_d12 g_d2 t y0 th) ![a0] ![v0] 0 ∧
    Gen.adj_gp_i_scalar_11_ng_out_0_3 g g_d1 g_d2 t y0 a0 b bu th thu v0
      = gProdTh (jet_scalar_11 f f_d1 f_d2 g g_d1 g_d11 g_d12 g_d2 t y0 th) ![a0] ![v0] 1 := by
  refine ⟨?_, ?_, ?_, ?_⟩ <;>
  simp [Gen.adj_gp_i_scalar_11_ng_out_0_0, Gen.adj_gp_i_scalar_11_ng_out_0_1, Gen.adj_gp_i_scalar_11_ng_out_0_2, Gen.adj_gp_i_scalar_11_ng_out_0_3, jet_scalar_11, stratDriftY, stratDriftA, stratDriftTh, itoDriftY, itoDriftA, itoDriftTh, gProdY, gProdA, gProdTh, gdgY, gdgA, gdgTh, driftY, driftA, driftTh, diffY, diffA, diffTh, itoCorr, itoCorrY, itoCorrTh, fStrat, fStratY, fStratTh, colCorrY, colCorrA, colCorrTh, Fin.sum_univ_two, Fin.sum_univ_one, Fin.isValue, Matrix.cons_val_zero, Matrix.cons_val_one, Matrix.cons_val_fin_one, Matrix.head_cons] <;> ring

theorem adj_gp_i_scalar_11_ng_unused_param_zero (f : K → K → K → K) (f_d1 : K → K → K → K) (f_d2 : K → K → K → K) (g : K → K → K → K) (g_d1 : K → K → K → K) (g_d11 : K → K → K → K) (g_d12 : K → K → K → K) (g_d2 : K → K → K → K) (t y0 a0 b bu th thu v0 : K) :
    Gen.adj_gp_i_scalar_11_ng_out_0_3 g g_d1 g_d2 t y0 a0 b bu th thu v0 = 0 := by
  simp [Gen.adj_gp_i_scalar_11_ng_out_0_3]

theorem adj_gp_i_scalar_11_ng_graph (f : K → K → K → K) (f_d1 : K → K → K → K) (f_d2 : K → K → K → K) (g : K → K → K → K) (g_d1 : K → K → K → K) (g_d11 : K → K → K → K) (g_d12 : K → K → K → K) (g_d2 : K → K → K → K) (t y0 a0 b bu th thu v0 : K) :
    Gen.adj_gp_i_scalar_11_ng_rg_out g g_d1 g_d2 t y0 a0 b bu th thu v0 = 0 ∧
    Gen.adj_gp_i_scalar_11_ng_leaf_out g g_d1 g_d2 t y0 a0 b bu th thu v0 = 1 ∧
    Gen.adj_gp_i_scalar_11_ng_rg_z_after g g_d1 g_d2 t y0 a0 b bu th thu v0 = 0 ∧
    Gen.adj_gp_i_scalar_11_ng_leaf_z_after g g_d1 g_d2 t y0 a0 b bu th thu v0 = 1 := by
  refine ⟨?_, ?_, ?_, ?_⟩ <;> simp only [Gen.adj_gp_i_scalar_11_ng_rg_out, Gen.adj_gp_i_scalar_11_ng_leaf_out, Gen.adj_gp_i_scalar_11_ng_rg_z_after, Gen.adj_gp_i_scalar_11_ng_leaf_z_after]

theorem adj_gp_i_scalar_11_en_spec (f : K → K → K → K) (f_d1 : K → K → K → K) (f_d2 : K → K → K → K) (g : K → K → K → K) (g_d1 : K → K → K → K) (g_d11 : K → K → K → K) (g_d12 : K → K → K → K) (g_d2 : K → K → K → K) (g_d22 : K → K → K → K) (t y0 a0 b bu th thu v0 : K) :
    Gen.adj_gp_i_scalar_11_en_out_0_0 g g_d1 g_d11 g_d12 g_d2 g_d22 t y0 a0 b bu th thu v0
      = gProdY (jet_scalar_11 f f_d1 f_d2 g g_d1 g_d11 g_d12 g_d2 t y0 th) ![v0] 0 ∧
    Gen.adj_gp_i_scalar_11_en_out_0_1 g g_d1 g_d11 g_d12 g_d2 g_d22 t y0 a0 b bu th thu v0
      = gProdA (jet_scalar_11 f f_d1 f_d2 g g_d1 g_d11 g_d12 g_d2 t y0 th) ![a0] ![v0] 0 ∧
    Gen.adj_gp_i_scalar_11_en_out_0_2 g g_d1 g_d11 g_d12 g_d2 g_d22 t y0 a0 b bu th thu v0
      = gProdTh (jet_scalar_11 f f_d1 f_d2 g g_d1 g_d11 g_d12 g_d2 t y0 th) ![a0] ![v0] 0 ∧
    Gen.adj_gp_i_scalar_11_en_out_0_3 g g_d1 g_d11 g_d12 g_d2 g_d22 t y0 a0 b bu th thu v0
      = gProdTh (jet_scalar_11 f f_d1 f_d2 g g_d1 g_d11 g_d12 g_d2 t y0 th) ![a0] ![v0] 1 := by
  refine ⟨?_, ?_, ?_, ?_⟩ <;>
  simp [Gen.adj_gp_i_scalar_11_en_out_0_0, Gen.adj_gp_i_scalar_11_en_out_0_1, Gen.adj_gp_i_scalar_11_en_out_0_2, Gen.adj_gp_i_scalar_11_en_out_0_3, jet_scalar_11, stratDriftY, stratDriftA, stratDriftTh, itoDriftY, itoDriftA, itoDriftTh, gProdY, gProdA, gProdTh, gdgY, gdgA, gdgTh, driftY, driftA, driftTh, diffY, diffA, diffTh, itoCorr, itoCorrY, itoCorrTh, fStrat, fStratY, fStratTh, colCorrY, colCorrA, colCorrTh, Fin.sum_univ_two, Fin.sum_univ_one, Fin.isValue, Matrix.cons_val_zero, Matrix.cons_val_one, Matrix.cons_val_fin_one, Matrix.head_cons] <;> ring

theorem adj_gp_i_scalar_11_en_unused_param_zero (f : K → K → K → K) (f_d1 : K → K → K → K) (f_d2 : K → K → K → K) (g : K → K → K → K) (g_d1 : K → K → K → K) (g_d11 : K → K → K → K) (g_d12 : K → K → K → K) (g_d2 : K → K → K → K) (g_d22 : K → K → K → K) (t y0 a0 b bu th thu v0 : K) :
    Gen.adj_gp_i_scalar_11_en_out_0_3 g g_d1 g_d11 g_d12 g_d2 g_d22 t y0 a0 b bu th thu v0 = 0 := by
  simp [Gen.adj_gp_i_scalar_11_en_out_0_3]

theorem adj_gp_i_scalar_11_en_graph (f : K → K → K → K) (f_d1 : K → K → K → K) (f_d2 : K → K → K → K) (g : K → K → K → K) (g_d1 : K → K → K → K) (g_d11 : K → K → K → K) (g_d12 : K → K → K → K) (g_d2 : K → K → K → K) (g_d22 : K → K → K → K) (t y0 a0 b bu th thu v0 : K) :
    Gen.adj_gp_i_scalar_11_en_rg_out g g_d1 g_d11 g_d12 g_d2 g_d22 t y0 a0 b bu th thu v0 = 1 ∧
    Gen.adj_gp_i_scalar_11_en_leaf_out g g_d1 g_d11 g_d12 g_d2 g_d22 t y0 a0 b bu th thu v0 = 0 ∧
    Gen.adj_gp_i_scalar_11_en_rg_z_after g g_d1 g_d11 g_d12 g_d2 g_d22 t y0 a0 b bu th thu v0 = 1 ∧
    Gen.adj_gp_i_scalar_11_en_leaf_z_after g g_d1 g_d11 g_d12 g_d2 g_d22 t y0 a0 b bu th thu v0 = 1 := by
  refine ⟨?_, ?_, ?_, ?_⟩ <;> simp only [Gen.adj_gp_i_scalar_11_en_rg_out, Gen.adj_gp_i_scalar_11_en_leaf_out, Gen.adj_gp_i_scalar_11_en_rg_z_after, Gen.adj_gp_i_scalar_11_en_leaf_z_after]

theorem adj_fgp_i_scalar_11_ng_unused_param_zero (f : K → K → K → K) (f_d1 : K → K → K → K) (f_d2 : K → K → K → K) (g : K → K → K → K) (g_d1 : K → K → K → K) (g_d11 : K → K → K → K) (g_d12 : K → K → K → K) (g_d2 : K → K → K → K) (t y0 a0 b bu th thu v0 : K) :
    Gen.adj_fgp_i_scalar_11_ng_f_0_3 f f_d1 f_d2 g g_d1 g_d11 g_d12 g_d2 t y0 a0 b bu th thu v0 = 0 ∧
    Gen.adj_fgp_i_scalar_11_ng_gp_0_3 f f_d1 f_d2 g g_d1 g_d11 g_d12 g_d2 t y0 a0 b bu th thu v0 = 0 := by
  refine ⟨?_, ?_⟩ <;> simp [Gen.adj_fgp_i_scalar_11_ng_f_0_3, Gen.adj_fgp_i_scalar_11_ng_gp_0_3]

theorem adj_fgp_i_scalar_11_ng_pair (f : K → K → K → K) (f_d1 : K → K → K → K) (f_d2 : K → K → K → K) (g : K → K → K → K) (g_d1 : K → K → K → K) (g_d11 : K → K → K → K) (g_d12 : K → K → K → K) (g_d2 : K → K → K → K) (t y0 a0 b bu th thu v0 : K) :
    Gen.adj_fgp_i_scalar_11_ng_f_0_0 f f_d1 f_d2 g g_d1 g_d11 g_d12 g_d2 t y0 a0 b bu th thu v0
      = Gen.adj_f_i_scalar_11_ng_out_0_0 f f_d1 f_d2 g g_d1 g_d11 g_d12 g_d2 t y0 a0 b bu th thu ∧
    Gen.adj_fgp_i_scalar_11_ng_f_0_1 f f_d1 f_d2 g g_d1 g_d11 g_d12 g_d2 t y0 a0 b bu th thu v0
      = Gen.adj_f_i_scalar_11_ng_out_0_1 f f_d1 f_d2 g g_d1 g_d11 g_d12 g_d2 t y0 a0 b bu th thu ∧
    Gen.adj_fgp_i_scalar_11_ng_f_0_2 f f_d1 f_d2 g g_d1 g_d11 g_d12 g_d2 t y0 a0 b bu th thu v0
      = Gen.adj_f_i_scalar_11_ng_out_0_2 f f_d1 f_d2 g g_d1 g_d11 g_d12 g_d2 t y0 a0 b bu th thu ∧
    Gen.adj_fgp_i_scalar_11_ng_f_0_3 f f_d1 f_d2 g g_d1 g_d11 g_d12 g_d2 t y0 a0 b bu th thu v0
      = Gen.adj_f_i_scalar_11_ng_out_0_3 f f_d1 f_d2 g g_d1 g_d11 g_d12 g_d2 t y0 a0 b bu th thu ∧
    Gen.adj_fgp_i_scalar_11_ng_gp_0_0 f f_d1 f_d2 g g_d1 g_d11 g_d12 g_d2 t y0 a0 b bu th thu v0
      = Gen.adj_gp_i_scalar_11_ng_out_0_0 g g_d1 g_d2 t y0 a0 b bu th thu v0 ∧
    Gen.adj_fgp_i_scalar_11_ng_gp_0_1 f f_d1 f_d2 g g_d1 g_d11 g_d12 g_d2 t y0 a0 b bu th thu v0
      = Gen.adj_gp_i_scalar_11_ng_out_0_1 g g_d1 g_d2 t y0 a0 b bu th thu v0 ∧
    Gen.adj_fgp_i_scalar_11_ng_gp_0_2 f f_d1 f_d2 g g_d1 g_d11 g_d12 g_d2 t y0 a0 b bu th thu v0
      = Gen.adj_gp_i_scalar_11_ng_out_0_2 g g_d1 g_d2 t y0 a0 b bu th thu v0 ∧
    Gen.adj_fgp_i_scalar_11_ng_gp_0_3 f f_d1 f_d2 g g_d1 g_d11 g_d12 g_d2 t y0 a0 b bu th thu v0
      = Gen.adj_gp_i_scalar_11_ng_out_0_3 g g_d1 g_d2 t y0 a0 b bu th thu v0 := by
  refine ⟨?_, ?_, ?_, ?_, ?_, ?_, ?_, ?_⟩ <;> simp only [Gen.adj_fgp_i_scalar_11_ng_f_0_0, Gen.adj_f_i_scalar_11_ng_out_0_0, Gen.adj_fgp_i_scalar_11_ng_f_0_1, Gen.adj_f_i_scalar_11_ng_out_0_1, Gen.adj_fgp_i_scalar_11_ng_f_0_2, Gen.adj_f_i_scalar_11_ng_out_0_2, Gen.adj_fgp_i_scalar_11_ng_f_0_3, Gen.adj_f_i_scalar_11_ng_out_0_3, Gen.adj_fgp_i_scalar_11_ng_gp_0_0, Gen.adj_gp_i_scalar_11_ng_out_0_0, Gen.adj_fgp_i_scalar_11_ng_gp_0_1, Gen.adj_gp_i_scalar_11_ng_out_0_1, Gen.adj_fgp_i_scalar_11_ng_gp_0_2, Gen.adj_gp_i_scalar_11_ng_out_0_2, Gen.adj_fgp_i_scalar_11_ng_gp_0_3, Gen.adj_gp_i_scalar_11_ng_out_0_3] <;> ring

theorem adj_fgp_i_scalar_11_ng_graph (f : K → K → K → K) (f_d1 : K → K → K → K) (f_d2 : K → K → K → K) (g : K → K → K → K) (g_d1 : K → K → K → K) (g_d11 : K → K → K → K) (g_d12 : K → K → K → K) (g_d2 : K → K → K → K) (t y0 a0 b bu th thu v0 : K) :
    Gen.adj_fgp_i_scalar_11_ng_rg_f f f_d1 f_d2 g g_d1 g_d11 g_d12 g_d2 t y0 a0 b bu th thu v0 = 0 ∧
    Gen.adj_fgp_i_scalar_11_ng_leaf_f f f_d1 f_d2 g g_d1 g_d11 g_d12 g_d2 t y0 a0 b bu th thu v0 = 1 ∧
    Gen.adj_fgp_i_scalar_11_ng_rg_gp f f_d1 f_d2 g g_d1 g_d11 g_d12 g_d2 t y0 a0 b bu th thu v0 = 0 ∧
    Gen.adj_fgp_i_scalar_11_ng_leaf_gp f f_d1 f_d2 g g_d1 g_d11 g_d12 g_d2 t y0 a0 b bu th thu v0 = 1 ∧
    Gen.adj_fgp_i_scalar_11_ng_rg_z_after f f_d1 f_d2 g g_d1 g_d11 g_d12 g_d2 t y0 a0 b bu th thu v0 = 0 ∧
    Gen.adj_fgp_i_scalar_11_ng_leaf_z_after f f_d1 f_d2 g g_d1 g_d11 g_d12 g_d2 t y0 a0 b bu th thu v0 = 1 := by
  refine ⟨?_, ?_, ?_, ?_, ?_, ?_⟩ <;> simp only [Gen.adj_fgp_i_scalar_11_ng_rg_f, Gen.adj_fgp_i_scalar_11_ng_leaf_f, Gen.adj_fgp_i_scalar_11_ng_rg_gp, Gen.adj_fgp_i_scalar_11_ng_leaf_gp, Gen.adj_fgp_i_scalar_11_ng_rg_z_after, Gen.adj_fgp_i_scalar_11_ng_leaf_z_after]

theorem adj_fgp_i_scalar_11_en_unused_param_zero (f : K → K → K → K) (f_d1 : K → K → K → K) (f_d2 : K → K → K → K) (g : K → K → K → K) (g_d1 : K → K → K → K) (g_d11 : K → K → K → K) (g_d12 : K → K → K → K) (g_d2 : K → K → K → K) (t y0 a0 b bu th thu v0 : K) :
    Gen.adj_fgp_i_scalar_11_en_f_0_3 f f_d1 f_d2 g g_d1 g_d11 g_d12 g_d2 t y0 a0 b bu th thu v0 = 0 ∧
    Gen.adj_fgp_i_scalar_11_en_gp_0_3 f f_d1 f_d2 g g_d1 g_d11 g_d12 g_d2 t y0 a0 b bu th thu v0 = 0 := by
  refine ⟨?_, ?_⟩ <;> simp [Gen.adj_fgp_i_scalar_11_en_f_0_3, Gen.adj_fgp_i_scalar_11_en_gp_0_3]

theorem adj_fgp_i_scalar_11_en_pair (f : K → K → K → K) (f_d1 : K → K → K → K) (f_d2 : K → K → K → K) (g : K → K → K → K) (g_d1 : K → K → K → K) (g_d11 : K → K → K → K) (g_d12 : K → K → K → K) (g_d2 : K → K → K → K) (t y0 a0 b bu th thu v0 : K) :
    Gen.adj_fgp_i_scalar_11_en_f_0_0 f f_d1 f_d2 g g_d1 g_d11 g_d12 g_d2 t y0 a0 b bu th thu v0
      = Gen.adj_f_i_scalar_11_en_out_0_0 f f_d1 f_d11 f_d12 f_d2 f_d22 g g_d1 g_d11 g_d111 g_d112 g_d12 g_d122 g_d2 g_d22 t y0 a0 b bu th thu ∧
    Gen.adj_fgp_i_scalar_11_en_f_0_1 f f_d1 f_d2 g g_d1 g_d11 g_d12 g_d2 t y0 a0 b bu th thu v0
      = Gen.adj_f_i_scalar_11_en_out_0_1 f f_d1 f_d11 f_d12 f_d2 f_d22 g g_d1 g_d11 g_d111 g_d112 g_d12 g_d122 g_d2 g_d22 t y0 a0 b bu th thu ∧
    Gen.adj_fgp_i_scalar_11_en_f_0_2 f f_d1 f_d2 g g_d1 g_d11 g_d12 g_d2 t y0 a0 b bu th thu v0
      = Gen.adj_f_i_scalar_11_en_out_0_2 f f_d1 f_d11 f_d12 f_d2 f_d22 g g_d1 g_d11 g_d111 g_d112 g_d12 g_d122 g_d2 g_d22 t y0 a0 b bu th thu ∧
    Gen.adj_fgp_i_scalar_11_en_f_0_3 f f_d1 f_d2 g g_d1 g_d11 g_d12 g_d2 t y0 a0 b bu th thu v0
      = Gen.adj_f_i_scalar_11_en_out_0_3 f f_d1 f_d11 f_d12 f_d2 f_d22 g g_d1 g_d11 g_d111 g_d112 g_d12 g_d122 g_d2 g_d22 t y0 a0 b bu th thu ∧
    Gen.adj_fgp_i_scalar_11_en_gp_0_0 f f_d1 f_d2 g g_d1 g_d11 g_d12 g_d2 t y0 a0 b bu th thu v0
      = Gen.adj_gp_i_scalar_11_en_out_0_0 g g_d1 g_d11 g_d12 g_d2 g_d22 t y0 a0 b bu th thu v0 ∧
    Gen.adj_fgp_i_scalar_11_en_gp_0_1 f f_d1 f_d2 g g_d1 g_d11 g_d12 g_d2 t y0 a0 b bu th thu v0
      = Gen.adj_gp_i_scalar_11_en_out_0_1 g g_d1 g_d11 g_d12 g_d2 g_d22 t y0 a0 b bu th thu v0 ∧
    Gen.adj_fgp_i_scalar_11_en_gp_0_2 f f_d1 f_d2 g g_d1 g_d11 g_d12 g_d2 t y0 a0 b bu th thu v0
      = Gen.adj_gp_i_scalar_11_en_out_0_2 g g_d1 g_d11 g_d12 g_d2 g_d22 t y0 a0 b bu th thu v0 ∧
    Gen.adj_fgp_i_scalar_11_en_gp_0_3 f f_d1 f_d2 g g_d1 g_d11 g_d12 g_d2 t y0 a0 b bu th thu v0
      = Gen.adj_gp_i_scalar_11_en_out_0_3 g g_d1 g_d11 g_d12 g_d2 g_d22 t y0 a0 b bu th thu v0 := by
  refine ⟨?_, ?_, ?_, ?_, ?_, ?_, ?_, ?_⟩ <;> simp only [Gen.adj_fgp_i_scalar_11_en_f_0_0, Gen.adj_f_i_scalar_11_en_out_0_0, Gen.adj_fgp_i_scalar_11_en_f_0_1, Gen.adj_f_i_scalar_11_en_out_0_1, Gen.adj_fgp_i_scalar_11_en_f_0_2, Gen.adj_f_i_scalar_11_en_out_0_2, Gen.adj_fgp_i_scalar_11_en_f_0_3, Gen.adj_f_i_scalar_11_en_out_0_3, Gen.adj_fgp_i_scalar_11_en_gp_0_0, Gen.adj_gp_i_scalar_11_en_out_0_0, Gen.adj_fgp_i_scalar_11_en_gp_0_1, Gen.adj_gp_i_scalar_11_en_out_0_1, Gen.adj_fgp_i_scalar_11_en_gp_0_2, Gen.adj_gp_i_scalar_11_en_out_0_2, Gen.adj_fgp_i_scalar_11_en_gp_0_3, Gen.adj_gp_i_scalar_11_en_out_0_3] <;> ring

theorem adj_fgp_i_scalar_11_en_graph (f : K → K → K → K) (f_d1 : K → K → K → K) (f_d2 : K → K → K → K) (g : K → K → K → K) (g_d1 : K → K → K → K) (g_d11 : K → K → K → K) (g_d12 : K → K → K → K) (g_d2 : K → K → K → K) (t y0 a0 b bu th thu v0 : K) :
    Gen.adj_fgp_i_scalar_11_en_rg_f f f_d1 f_d2 g g_d1 g_d11 g_d12 g_d2 t y0 a0 b bu th thu v0 = 1 ∧
    Gen.adj_fgp_i_scalar_11_en_leaf_f f f_d1 f_d2 g g_d1 g_d11 g_d12 g_d2 t y0 a0 b bu th thu v0 = 0 ∧
    Gen.adj_fgp_i_scalar_11_en_rg_gp f f_d1 f_d2 g g_d1 g_d11 g_d12 g_d2 t y0 a0 b bu th thu v0 = 1 ∧
    Gen.adj_fgp_i_scalar_11_en_leaf_gp f f_d1 f_d2 g g_d1 g_d11 g_d12 g_d2 t y0 a0 b bu th thu v0 = 0 ∧
    Gen.adj_fgp_i_scalar_11_en_rg_z_after f f_d1 f_d2 g g_d1 g_d11 g_d12 g_d2 t y0 a0 b bu th thu v0 = 1 ∧
    Gen.adj_fgp_i_scalar_11_en_leaf_z_after f f_d1 f_d2 g g_d1 g_d11 g_d12 g_d2 t y0 a0 b bu th thu v0 = 1 := by
  refine ⟨?_, ?_, ?_, ?_, ?_, ?_⟩ <;> simp only [Gen.adj_fgp_i_scalar_11_en_rg_f, Gen.adj_fgp_i_scalar_11_en_leaf_f, Gen.adj_fgp_i_scalar_11_en_rg_gp, Gen.adj_fgp_i_scalar_11_en_leaf_gp, Gen.adj_fgp_i_scalar_11_en_rg_z_after, Gen.adj_fgp_i_scalar_11_en_leaf_z_after]

theorem adj_f_i_scalar_21_ng_spec (f0 : K → K → K → K → K) (f0_d1 : K → K → K → K → K) (f0_d2 : K → K → K → K → K) (f0_d3 : K → K → K → K → K) (f1 : K → K → K → K → K) (f1_d1 : K → K → K → K → K) (f1_d2 : K → K → K → K → K) (f1_d3 : K → K → K → K → K) (g00 : K → K → K → K → K) (g00_d1 : K → K → K → K → K) (g00_d11 : K → K → K → K → K) (g00_d12 : K → K → K → K → K) (g00_d13 : K → K → K → K → K) (g00_d2 : K → K → K → K → K) (g00_d22 : K → K → K → K → K) (g00_d23 : K → K → K → K → K) (g00_d3 : K → K → K → K → K) (g10 : K → K → K → K → K) (g10_d1 : K → K → K → K → K) (g10_d11 : K → K → K → K → K) (g10_d12 : K → K → K → K → K) (g10_d13 : K → K → K → K → K) (g10_d2 : K → K → K → K → K) (g10_d22 : K → K → K → K → K) (g10_d23 : K → K → K → K → K) (g10_d3 : K → K → K → K → K) (t y0 y1 a0 a1 b bu th thu : K) :
    Gen.adj_f_i_scalar_21_ng_out_0_0 f0 f0_d1 f0_d2 f0_d3 f1 f1_d1 f1_d2 f1_d3 g00 g00_d1 g00_d11 g00_d12 g00_d13 g00_d2 g00_d22 g00_d23 g00_d3 g10 g10_d1 g10_d11 g10_d12 g10_d13 g10_d2 g10_d22 g10_d23 g10_d3 t y0 y1 a0 a1 b bu th thu
      = itoDriftY (jet_scalar_21 f0 f0_d1 f0_d2 f0_d3 f1 f1_d1 f1_d2 f1_d3 g00 g00_d1 g00_d11 g00_d12 g00_d13 g00_d2 g00_d22 g00_d23 g00_d3 g10 g10_d1 g10_d11 g10_d12 g10_d13 g10_d2 g10_d22 g10_d23 g10_d3 t y0 y1 th) 0 ∧
    Gen.adj_f_i_scalar_21_ng_out_0_1 f0 f0_d1 f0_d2 f0_d3 f1 f1_d1 f1_d2 f1_d3 g00 g00_d1 g00_d11 g00_d12 g00_d13 g00_d2 g00_d22 g00_d23 g00_d3 g10 g10_d1 g10_d11 g10_d12 g10_d13 g10_d2 g10_d22 g10_d23 g10_d3 t y0 y1 a0 a1 b bu th thu
      = itoDriftY (jet_scalar_21 f0 f0_d1 f0_d2 f0_d3 f1 f1_d1 f1_d2 f1_d3 g00 g00_d1 g00_d11 g00_d12 g00_d13 g00_d2 g00_d22 g00_d23 g00_d3 g10 g10_d1 g10_d11 g10_d12 g10_d13 g10_d2 g10_d22 g10_d23 g10_d3 t y0 y1 th) 1 ∧
    Gen.adj_f_i_scalar_21_ng_out_0_2 f0 f0_d1 f0_d2 f0_d3 f1 f1_d1 f1_d2 f1_d3 g00 g00_d1 g00_d11 g00_d12 g00_d13 g00_d2 g00_d22 g00_d23 g00_d3 g10 g10_d1 g10_d11 g10_d12 g10_d13 g10_d2 g10_d22 g10_d23 g10_d3 t y0 y1 a0 a1 b bu th thu
      = itoDriftA (jet_scalar_21 f0 f0_d1 f0_d2 f0_d3 f1 f1_d1 f1_d2 f1_d3 g00 g00_d1 g00_d11 g00_d12 g00_d13 g00_d2 g00_d22 g00_d23 g00_d3 g10 g10_d1 g10_d11 g10_d12 g10_d13 g10_d2 g10_d22 g10_d23 g10_d3 t y0 y1 th) ![a0, a1] 0 ∧
    Gen.adj_f_i_scalar_21_ng_out_0_3 f0 f0_d1 f0_d2 f0_d3 f1 f1_d1 f1_d2 f1_d3 g00 g00_d1 g00_d11 g00_d12 g00_d13 g00_d2 g00_d22 g00_d23 g00_d3 g10 g10_d1 g10_d11 g10_d12 g10_d13 g10_d2 g10_d22 g10_d23 g10_d3 t y0 y1 a0 a1 b bu th thu
      = itoDriftA (jet_scalar_21 f0 f0_d1 f0_d2 f0_d3 f1 f1_d1 f1_d2 f1_d3 g00 g00_d1 g00_d11 g00_d12 g00_d13 g00_d2 g00_d22 g00_d23 g00_d3 g10 g10_d1 g10_d11 g10_d12 g10_d13 g10_d2 g10_d22 g10_d23 g10_d3 t y0 y1 th) ![a0, a1] 1 ∧
    Gen.adj_f_i_scalar_21_ng_out_0_4 f0 f0_d1 f0_d2 f0_d3 f1 f1_d1 f1_d2 f1_d3 g00 g00_d1 g00_d11 g00_d12 g00_d13 g00_d2 g00_d22 g00_d23 g00_d3 g10 g10_d1 g10_d11 g10_d12 g10_d13 g10_d2 g10_d22 g10_d23 g10_d3 t y0 y1 a0 a1 b bu th thu
      = itoDriftTh (jet_scalar_21 f0 f0_d1 f0_d2 f0_d3 f1 f1_d1 f1_d2 f1_d3 g00 g00_d1 g00_d11 g00_d12 g00_d13 g00_d2 g00_d22 g00_d23 g00_d3 g10 g10_d1 g10_d11 g10_d12 g10_d13 g10_d2 g10_d22 g10_d23 g10_d3 t y0 y1 th) ![a0, a1] 0 ∧
    Gen.adj_f_i_scalar_21_ng_out_0_5 f0 f0_d1 f0_d2 f0_d3 f1 f1_d1 f1_d2 f1_d3 g00 g00_d1 g00_d11 g00_d12 g00_d13 g00_d2 g00_d22 g00_d23 g00_d3 g10 g10_d1 g10_d11 g10_d12 g10_d13 g10_d2 g10_d22 g10_d23 g10_d3 t y0 y1 a0 a1 b bu th thu
      = itoDriftTh (jet_scalar_21 f0 f0_d1 f0_d2 f0_d3 f1 f1_d1 f1_d2 f1_d3 g00 g00_d1 g00_d11 g00_d12 g00_d13 g00_d2 g00_d22 g00_d23 g00_d3 g10 g10_d1 g10_d11 g10_d12 g10_d13 g10_d2 g10_d22 g10_d23 g10_d3 t y0 y1 th) ![a0, a1] 1 := by
  refine ⟨?_, ?_, ?_, ?_, ?_, ?_⟩ <;>
  simp [Gen.adj_f_i_scalar_21_ng_out_0_0, Gen.adj_f_i_scalar_21_ng_out_0_1, Gen.adj_f_i_scalar_21_ng_out_0_2, Gen.adj_f_i_scalar_21_ng_out_0_3, Gen.adj_f_i_scalar_21_ng_out_0_4, Gen.adj_f_i_scalar_21_ng_out_0_5, jet_scalar_21, stratDriftY, stratDriftA, stratDriftTh, itoDriftY, itoDriftA, itoDriftTh, gProdY, gProdA, gProdTh, gdgY, gdgA, gdgTh, driftY, driftA, driftTh, diffY, diffA, diffTh, itoCorr, itoCorrY, itoCorrTh, fStrat, fStratY, fStratTh, colCorrY, colCorrA, colCorrTh, Fin.sum_univ_two, Fin.sum_univ_one, Fin.isValue, Matrix.cons_val_zero, Matrix.cons_val_one, Matrix.cons_val_fin_one, Matrix.head_cons] <;> ring

theorem adj_f_i_scalar_21_ng_unused_param_zero (f0 : K → K → K → K → K) (f0_d1 : K → K → K → K → K) (f0_d2 : K → K → K → K → K) (f0_d3 : K → K → K → K → K) (f1 : K → K → K → K → K) (f1_d1 : K → K → K → K → K) (f1_d2 : K → K → K → K → K) (f1_d3 : K → K → K → K → K) (g00 : K → K → K → K → K) (g00_d1 : K → K → K → K → K) (g00_d11 : K → K → K → K → K) (g00_d12 : K → K → K → K → K) (g00_d13 : K → K → K → K → K) (g00_d2 : K → K → K → K → K) (g00_d22 : K → K → K → K → K) (g00_d23 : K → K → K → K → K) (g00_d3 : K → K → K → K → K) (g10 : K → K → K → K → K) (g10_d1 : K → K → K → K → K) (g10_d11 : K → K → K → K → K) (g10_d12 : K → K → K → K → K) (g10_d13 : K → K → K → K → K) (g10_d2 : K → K → K → K → K) (g10_d22 : K → K → K → K → K) (g10_d23 : K → K → K → K → K) (g10_d3 : K → K → K → K → K) (t y0 y1 a0 a1 b bu th thu : K) :
    Gen.adj_f_i_scalar_21_ng_out_0_5 f0 f0_d1 f0_d2 f0_d3 f1 f1_d1 f1_d2 f1_d3 g00 g00_d1 g00_d11 g00_d12 g00_d13 g00_d2 g00_d22 g00_d23 g00_d3 g10 g10_d1 g10_d11 g10_d12 g10_d13 g10_d2 g10_d22 g10_d23 g10_d3 t y0 y1 a0 a1 b bu th thu = 0 := by
  simp [Gen.adj_f_i_scalar_21_ng_out_0_5]

theorem adj_f_i_scalar_21_ng_graph (f0 : K → K → K → K → K) (f0_d1 : K → K → K → K → K) (f0_d2 : K → K → K → K → K) (f0_d3 : K → K → K → K → K) (f1 : K → K → K → K → K) (f1_d1 : K → K → K → K → K) (f1_d2 : K → K → K → K → K) (f1_d3 : K → K → K → K → K) (g00 : K → K → K → K → K) (g00_d1 : K → K → K → K → K) (g00_d11 : K → K → K → K → K) (g00_d12 : K → K → K → K → K) (g00_d13 : K → K → K → K → K) (g00_d2 : K → K → K → K → K) (g00_d22 : K → K → K → K → K) (g00_d23 : K → K → K → K → K) (g00_d3 : K → K → K → K → K) (g10 : K → K → K → K → K) (g10_d1 : K → K → K → K → K) (g10_d11 : K → K → K → K → K) (g10_d12 : K → K → K → K → K) (g10_d13 : K → K → K → K → K) (g10_d2 : K → K → K → K → K) (g10_d22 : K → K → K → K → K) (g10_d23 : K → K → K → K → K) (g10_d3 : K → K → K → K → K) (t y0 y1 a0 a1 b bu th thu : K) :
    Gen.adj_f_i_scalar_21_ng_rg_out f0 f0_d1 f0_d2 f0_d3 f1 f1_d1 f1_d2 f1_d3 g00 g00_d1 g00_d11 g00_d12 g00_d13 g00_d2 g00_d22 g00_d23 g00_d3 g10 g10_d1 g10_d11 g10_d12 g10_d13 g10_d2 g10_d22 g10_d23 g10_d3 t y0 y1 a0 a1 b bu th thu = 0 ∧
    Gen.adj_f_i_scalar_21_ng_leaf_out f0 f0_d1 f0_d2 f0_d3 f1 f1_d1 f1_d2 f1_d3 g00 g00_d1 g00_d11 g00_d12 g00_d13 g00_d2 g00_d22 g00_d23 g00_d3 g10 g10_d1 g10_d11 g10_d12 g10_d13 g10_d2 g10_d22 g10_d23 g10_d3 t y0 y1 a0 a1 b bu th thu = 1 ∧
    Gen.adj_f_i_scalar_21_ng_rg_z_after f0 f0_d1 f0_d2 f0_d3 f1 f1_d1 f1_d2 f1_d3 g00 g00_d1 g00_d11 g00_d12 g00_d13 g00_d2 g00_d22 g00_d23 g00_d3 g10 g10_d1 g10_d11 g10_d12 g10_d13 g10_d2 g10_d22 g10_d23 g10_d3 t y0 y1 a0 a1 b bu th thu = 0 ∧
    Gen.adj_f_i_scalar_21_ng_leaf_z_after f0 f0_d1 f0_d2 f0_d3 f1 f1_d1 f1_d2 f1_d3 g00 g00_d1 g00_d11 g00_d12 g00_d13 g00_d2 g00_d22 g00_d23 g00_d3 g10 g10_d1 g10_d11 g10_d12 g10_d13 g10_d2 g10_d22 g10_d23 g10_d3 t y0 y1 a0 a1 b bu th thu = 1 := by
  refine ⟨?_, ?_, ?_, ?_⟩ <;> simp only [Gen.adj_f_i_scalar_21_ng_rg_out, Gen.adj_f_i_scalar_21_ng_leaf_out, Gen.adj_f_i_scalar_21_ng_rg_z_after, Gen.adj_f_i_scalar_21_ng_leaf_z_after]

theorem adj_f_i_scalar_21_en_spec (f0 : K → K → K → K → K) (f0_d1 : K → K → K → K → K) (f0_d2 : K → K → K → K → K) (f0_d3 : K → K → K → K → K) (f1 : K → K → K → K → K) (f1_d1 : K → K → K → K → K) (f1_d2 : K → K → K → K → K) (f1_d3 : K → K → K → K → K) (g00 : K → K → K → K → K) (g00_d1 : K → K → K → K → K) (g00_d11 : K → K → K → K → K) (g00_d12 : K → K → K → K → K) (g00_d13 : K → K → K → K → K) (g00_d2 : K → K → K → K → K) (g00_d22 : K → K → K → K → K) (g00_d23 : K → K → K → K → K) (g00_d3 : K → K → K → K → K) (g10 : K → K → K → K → K) (g10_d1 : K → K → K → K → K) (g10_d11 : K → K → K → K → K) (g10_d12 : K → K → K → K → K) (g10_d13 : K → K → K → K → K) (g10_d2 : K → K → K → K → K) (g10_d22 : K → K → K → K → K) (g10_d23 : K → K → K → K → K) (g10_d3 : K → K → K → K → K) (t y0 y1 a0 a1 b bu th thu : K) :
    Gen.adj_f_i_scalar_21_en_out_0_0 f0 f0_d1 f0_d2 f0_d3 f1 f1_d1 f1_d2 f1_d3 g00 g00_d1 g00_d11 g00_d12 g00_d13 g00_d2 g00_d22 g00_d23 g00_d3 g10 g10_d1 g10_d11 g10_d12 g10_d13 g10_d2 g10_d22 g10_d23 g10_d3 t y0 y1 a0 a1 b bu th thu
      = itoDriftY (jet_scalar_21 f0 f0_d1 f0_d2 f0_d3 f1 f1_d1 f1_d2 f1_d3 g00 g00_d1 g00_d11 g00_d12 g00_d13 g00_d2 g00_d22 g00_d23 g00_d3 g10 g10_d1 g10_d11 g10_d12 g10_d13 g10_d2 g10_d22 g10_d23 g10_d3 t y0 y1 th) 0 ∧
    Gen.adj_f_i_scalar_21_en_out_0_1 f0 f0_d1 f0_d2 f0_d3 f1 f1_d1 f1_d2 f1_d3 g00 g00_d1 g00_d11 g00_d12 g00_d13 g00_d2 g00_d22 g00_d23 g00_d3 g10 g10_d1 g10_d11 g10_d12 g10_d13 g10_d2 g10_d22 g10_d23 g10_d3 t y0 y1 a0 a1 b bu th thu
      = itoDriftY (jet_scalar_21 f0 f0_d1 f0_d2 f0_d3 f1 f1_d1 f1_d2 f1_d3 g00 g00_d1 g00_d11 g00_d12 g00_d13 g00_d2 g00_d22 g00_d23 g00_d3 g10 g10_d1 g10_d11 g10_d12 g10_d13 g10_d2 g10_d22 g10_d23 g10_d3 t y0 y1 th) 1 ∧
    Gen.adj_f_i_scalar_21_en_out_0_2 f0 f0_d1 f0_d2 f0_d3 f1 f1_d1 f1_d2 f1_d3 g00 g00_d1 g00_d11 g00_d12 g00_d13 g00_d2 g00_d22 g00_d23 g00_d3 g10 g10_d1 g10_d11 g10_d12 g10_d13 g10_d2 g10_d22 g10_d23 g10_d3 t y0 y1 a0 a1 b bu th thu
      = itoDriftA (jet_scalar_21 f0 f0_d1 f0_d2 f0_d3 f1 f1_d1 f1_d2 f1_d3 g00 g00_d1 g00_d11 g00_d12 g00_d13 g00_d2 g00_d22 g00_d23 g00_d3 g10 g10_d1 g10_d11 g10_d12 g10_d13 g10_d2 g10_d22 g10_d23 g10_d3 t y0 y1 th) ![a0, a1] 0 ∧
    Gen.adj_f_i_scalar_21_en_out_0_3 f0 f0_d1 f0_d2 f0_d3 f1 f1_d1 f1_d2 f1_d3 g00 g00_d1 g00_d11 g00_d12 g00_d13 g00_d2 g00_d22 g00_d23 g00_d3 g10 g10_d1 g10_d11 g10_d12 g10_d13 g10_d2 g10_d22 g10_d23 g10_d3 t y0 y1 a0 a1 b bu th thu
      = itoDriftA (jet_scalar_21 f0 f0_d1 f0_d2 f0_d3 f1 f1_d1 f1_d2 f1_d3 g00 g00_d1 g00_d11 g00_d12 g00_d13 g00_d2 g00_d22 g00_d23 g00_d3 g10 g10_d1 g10_d11 g10_d12 g10_d13 g10_d2 g10_d22 g10_d23 g10_d3 t y0 y1 th) ![a0, a1] 1 ∧
    Gen.adj_f_i_scalar_21_en_out_0_4 f0 f0_d1 f0_d2 f0_d3 f1 f1_d1 f1_d2 f1_d3 g00 g00_d1 g00_d11 g00_d12 g00_d13 g00_d2 g00_d22 g00_d23 g00_d3 g10 g10_d1 g10_d11 g10_d12 g10_d13 g10_d2 g10_d22 g10_d23 g10_d3 t y0 y1 a0 a1 b bu th thu
      = itoDriftTh (jet_scalar_21 f0 f0_d1 f0_d2 f0_d3 f1 f1_d1 f1_d2 f1_d3 g00 g00_d1 g00_d11 g00_d12 g00_d13 g00_d2 g00_d22 g00_d23 g00_d3 g10 g10_d1 g10_d11 g10_d12 g10_d13 g10_d2 g10_d22 g10_d23 g10_d3 t y0 y1 th) ![a0, a1] 0 ∧
    Gen.adj_f_i_scalar_21_en_out_0_5 f0 f0_d1 f0_d2 f0_d3 f1 f1_d1 f1_d2 f1_d3 g00 g00_d1 g00_d11 g00_d12 g00_d13 g00_d2 g00_d22 g00_d23 g00_d3 g10 g10_d1 g10_d11 g10_d12 g10_d13 g10_d2 g10_d22 g10_d23 g10_d3 t y0 y1 a0 a1 b bu th thu
      = itoDriftTh (jet_scalar_21 f0 f0_d1 f0_d2 f0_d3 f1 f1_d1 f1_d2 f1_d3 g00 g00_d1 g00_d11 g00_d12 g00_d13 g00_d2 g00_d22 g00_d23 g00_d3 g10 g10_d1 g10_d11 g10_d12 g10_d13 g10_d2 g10_d22 g10_d23 g10_d3 t y0 y1 th) ![a0, a1] 1 := by
  refine ⟨?_, ?_, ?_, ?_, ?_, ?_⟩ <;>
  simp [Gen.adj_f_i_scalar_21_en_out_0_0, Gen.adj_f_i_scalar_21_en_out_0_1, Gen.adj_f_i_scalar_21_en_out_0_2, Gen.adj_f_i_scalar_21_en_out_0_3, Gen.adj_f_i_scalar_21_en_out_0_4, Gen.adj_f_i_scalar_21_en_out_0_5, jet_scalar_21, stratDriftY, stratDriftA, stratDriftTh, itoDriftY, itoDriftA, itoDriftTh, gProdY, gProdA, gProdTh, gdgY, gdgA, gdgTh, driftY, driftA, driftTh, diffY, diffA, diffTh, itoCorr, itoCorrY, itoCorrTh, fStrat, fStratY, fStratTh, colCorrY, colCorrA, colCorrTh, Fin.sum_univ_two, Fin.sum_univ_one, Fin.isValue, Matrix.cons_val_zero, Matrix.cons_val_one, Matrix.cons_val_fin_one, Matrix.head_cons] <;> ring

theorem adj_f_i_scalar_21_en_unused_param_zero (f0 : K → K → K → K → K) (f0_d1 : K → K → K → K → K) (f0_d2 : K → K → K → K → K) (f0_d3 : K → K → K → K → K) (f1 : K → K → K → K → K) (f1_d1 : K → K → K → K → K) (f1_d2 : K → K → K → K → K) (f1_d3 : K → K → K → K → K) (g00 : K → K → K → K → K) (g00_d1 : K → K → K → K → K) (g00_d11 : K → K → K → K → K) (g00_d12 : K → K → K → K → K) (g00_d13 : K → K → K → K → K) (g00_d2 : K → K → K → K → K) (g00_d22 : K → K → K → K → K) (g00_d23 : K → K → K → K → K) (g00_d3 : K → K → K → K → K) (g10 : K → K → K → K → K) (g10_d1 : K → K → K → K → K) (g10_d11 : K → K → K → K → K) (g10_d12 : K → K → K → K → K) (g10_d13 : K → K → K → K → K) (g10_d2 : K → K → K → K → K) (g10_d22 : K → K → K → K → K) (g10_d23 : K → K → K → K → K) (g10_d3 : K → K → K → K → K) (t y0 y1 a0 a1 b bu th thu : K) :
    Gen.adj_f_i_scalar_21_en_out_0_5 f0 f0_d1 f0_d2 f0_d3 f1 f1_d1 f1_d2 f1_d3 g00 g00_d1 g00_d11 g00_d12 g00_d13 g00_d2 g00_d22 g00_d23 g00_d3 g10 g10_d1 g10_d11 g10_d12 g10_d13 g10_d2 g10_d22 g10_d23 g10_d3 t y0 y1 a0 a1 b bu th thu = 0 := by
  simp [Gen.adj_f_i_scalar_21_en_out_0_5]

theorem adj_f_i_scalar_21_en_graph (f0 : K → K → K → K → K) (f0_d1 : K → K → K → K → K) (f0_d2 : K → K → K → K → K) (f0_d3 : K → K → K → K → K) (f1 : K → K → K → K → K) (f1_d1 : K → K → K → K → K) (f1_d2 : K → K → K → K → K) (f1_d3 : K → K → K → K → K) (g00 : K → K → K → K → K) (g00_d1 : K → K → K → K → K) (g00_d11 : K → K → K → K → K) (g00_d12 : K → K → K → K → K) (g00_d13 : K → K → K → K → K) (g00_d2 : K → K → K → K → K) (g00_d22 : K → K → K → K → K) (g00_d23 : K → K → K → K → K) (g00_d3 : K → K → K → K → K) (g10 : K → K → K → K → K) (g10_d1 : K → K → K → K → K) (g10_d11 : K → K → K → K → K) (g10_d12 : K → K → K → K → K) (g10_d13 : K → K → K → K → K) (g10_d2 : K → K → K → K → K) (g10_d22 : K → K → K → K → K) (g10_d23 : K → K → K → K → K) (g10_d3 : K → K → K → K → K) (t y0 y1 a0 a1 b bu th thu : K) :
    Gen.adj_f_i_scalar_21_en_rg_out f0 f0_d1 f0_d2 f0_d3 f1 f1_d1 f1_d2 f1_d3 g00 g00_d1 g00_d11 g00_d12 g00_d13 g00_d2 g00_d22 g00_d23 g00_d3 g10 g10_d1 g10_d11 g10_d12 g10_d13 g10_d2 g10_d22 g10_d23 g10_d3 t y0 y1 a0 a1 b bu th thu = 1 ∧
    Gen.adj_f_i_scalar_21_en_leaf_out f0 f0_d1 f0_d2 f0_d3 f1 f1_d1 f1_d2 f1_d3 g00 g00_d1 g00_d11 g00_d12 g00_d13 g00_d2 g00_d22 g00_d23 g00_d3 g10 g10_d1 g10_d11 g10_d12 g10_d13 g10_d2 g10_d22 g10_d23 g10_d3 t y0 y1 a0 a1 b bu th thu = 0 ∧
    Gen.adj_f_i_scalar_21_en_rg_z_after f0 f0_d1 f0_d2 f0_d3 f1 f1_d1 f1_d2 f1_d3 g00 g00_d1 g00_d11 g00_d12 g00_d13 g00_d2 g00_d22 g00_d23 g00_d3 g10 g10_d1 g10_d11 g10_d12 g10_d13 g10_d2 g10_d22 g10_d23 g10_d3 t y0 y1 a0 a1 b bu th thu = 1 ∧
    Gen.adj_f_i_scalar_21_en_leaf_z_after f0 f0_d1 f0_d2 f0_d3 f1 f1_d1 f1_d2 f1_d3 g00 g00_d1 g00_d11 g00_d12 g00_d13 g00_d2 g00_d22 g00_d23 g00_d3 g10 g10_d1 g10_d11 g10_d12 g10_d13 g10_d2 g10_d22 g10_d23 g10_d3 t y0 y1 a0 a1 b bu th thu = 1 := by
  refine ⟨?_, ?_, ?_, ?_⟩ <;> simp only [Gen.adj_f_i_scalar_21_en_rg_out, Gen.adj_f_i_scalar_21_en_leaf_out, Gen.adj_f_i_scalar_21_en_rg_z_after, Gen.adj_f_i_scalar_21_en_leaf_z_after]

theorem adj_gp_i_scalar_21_ng_spec (f0 : K → K → K → K → K) (f0_d1 : K → K → K → K → K) (f0_d2 : K → K → K → K → K) (f0_d3 : K → K → K → K → K) (f1 : K → K → K → K → K) (f1_d1 : K → K → K → K → K) (f1_d2 : K → K → K → K → K) (f1_d3 : K → K → K → K → K) (g00 : K → K → K → K → K) (g00_d1 : K → K → K → K → K) (g00_d11 : K → K → K → K → K) (g00_d12 : K → K → K → K → K) (g00_d13 : K → K → K → K → K) (g00_d2 : K → K → K → K → K) (g00_d22 : K → K → K → K → K) (g00_d23 : K → K → K → K → K) (g00_d3 : K → K → K → K → K) (g10 : K → K → K → K → K) (g10_d1 : K → K → K → K → K) (g10_d11 : K → K → K → K → K) (g10_d12 : K → K → K → K → K) (g10_d13 : K → K → K → K → K) (g10_d2 : K → K → K → K → K) (g10_d22 : K → K → K → K → K) (g10_d23 : K → K → K → K → K) (g10_d3 : K → K → K → K → K) (t y0 y1 a0 a1 b bu th thu v0 : K) :
    Gen.adj_gp_i_scalar_21_ng_out_0_0 g00 g00_d1 g00_d2 g00_d3 g10 g10_d1 g10_d2 g10_d3 t y0 y1 a0 a1 b bu th thu v0
      = gProdY (jet_scalar_21 f0 f0_d1 f0_d2 f0_d3 f1 f1_d1 f1_d2 f1_d3 g00 g00_d1 g00_d11 g00_d12 g00_d13 g00_d2 g00_d22 g00_d23 g00_d3 g10 g10_d1 g10_d11 g10_d12 g10_d13 g10_d2 g10_d22 g10_d23 g10_d3 t y0 y1 th) ![v0] 0 ∧
    Gen.adj_gp_i_scalar_21_ng_out_0_1 g00 g00_d1 g00_d2 g00_d3 g10 g10_d1 g10_d2 g10_d3 t y0 y1 a0 a1 b bu th thu v0
      = gProdY (jet_scalar_21 f0 f0_d1 f0_d2 f0_d3 f1 f1_d1 f1_d2 f1_d3 g00 g00_d1 g00_d11 g00_d12 g00_d13 g00_d2 g00_d22 g00_d23 g00_d3 g10 g10_d1 g10_d11 g10_d12 g10_d13 g10_d2 g10_d22 g10_d23 g10_d3 t y0 y1 th) ![v0] 1 ∧
    Gen.adj_gp_i_scalar_21_ng_out_0_2 g00 g00_d1 g00_d2 g00_d3 g10 g10_d1 g10_d2 g10_d3 t y0 y1 a0 a1 b bu th thu v0
      = gProdA (jet_scalar_21 f0 f0_d1 f0_d2 f0_d3 f1 f1_d1 f1_d2 f1_d3 g00 g00_d1 g00_d11 g00_d12 g00_d13 g00_d2 g00_d22 g00_d23 g00_d3 g10 g10_d1 g10_d11 g10_d12 g10_d13 g10_d2 g10_d22 g10_d23 g10_d3 t y0 y1 th) ![a0, a1] ![v0] 0 ∧
    Gen.adj_gp_i_scalar_21_ng_out_0_3 g00 g00_d1 g00_d2 g00_d3 g10 g10_d1 g10_d2 g10_d3 t y0 y1 a0 a1 b bu th thu v0
      = gProdA (jet_scalar_21 f0 f0_d1 f0_d2 f0_d3 f1 f1_d1 f1_d2 f1_d3 g00 g00_d1 g00_d11 g00_d12 g00_d13 g00_d2 g00_d22 g00_d23 g00_d3 g10 g10_d1 g10_d11 g10_d12 g10_d13 g10_d2 g10_d22 g10_d23 g10_d3 t y0 y1 th) ![a0, a1] ![v0] 1 ∧
    Gen.adj_gp_i_scalar_21_ng_out_0_4 g00 g00_d1 g00_d2 g00_d3 g10 g10_d1 g10_d2 g10_d3 t y0 y1 a0 a1 b bu th thu v0
      = gProdTh (jet_scalar_21 f0 f0_d1 f0_d2 f0_d3 f1 f1_d1 f1_d2 f1_d3 g00 g00_d1 g00_d11 g00_d12 g00_d13 g00_d2 g00_d22 g00_d23 g00_d3 g10 g10_d1 g10_d11 g10_d12 g10_d13 g10_d2 g10_d22 g10_d23 g10_d3 t y0 y1 th) ![a0, a1] ![v0] 0 ∧
    Gen.adj_gp_i_scalar_21_ng_out_0_5 g00 g00_d1 g00_d2 g00_d3 g10 g10_d1 g10_d2 g10_d3 t y0 y1 a0 a1 b bu th thu v0
      = gProdTh (jet_scalar_21 f0 f0_d1 f0_d2 f0_d3 f1 f1_d1 f1_d2 f1_d3 g00 g00_d1 g00_d11 g00_d12 g00_d13 g00_d2 g00_d22 g00_d23 g00_d3 g10 g10_d1 g10_d11 g10_d12 g10_d13 g10_d2 g10_d22 g10_d23 g10_d3 t y0 y1 th) ![a0, a1] ![v0] 1 := by
  refine ⟨?_, ?_, ?_, ?_, ?_, ?_⟩ <;>
  simp [Gen.adj_gp_i_scalar_21_ng_out_0_0, Gen.adj_gp_i_scalar_21_ng_out_0_1, Gen.adj_gp_i_scalar_21_ng_out_0_2, Gen.adj_gp_i_scalar_21_ng_out_0_3, Gen.adj_gp_i_scalar_21_ng_out_0_4, Gen.adj_gp_i_scalar_21_ng_out_0_5, jet_scalar_21, stratDriftY, stratDriftA, stratDriftTh, itoDriftY, itoDriftA, itoDriftTh, gProdY, gProdA, gProdTh, gdgY, gdgA, gdgTh, driftY, driftA, driftTh, diffY, diffA, diffTh, itoCorr, itoCorrY, itoCorrTh, fStrat, fStratY, fStratTh, colCorrY, colCorrA, colCorrTh, Fin.sum_univ_two, Fin.sum_univ_one, Fin.isValue, Matrix.cons_val_zero, Matrix.cons_val_one, Matrix.cons_val_fin_one, Matrix.head_cons] <;> ring

theorem adj_gp_i_scalar_21_ng_unused_param_zero (f0 : K → K → K → K → K) (f0_d1 : K → K → K → K → K) (f0_d2 : K → K → K → K → K) (f0_d3 : K → K → K → K → K) (f1 : K → K → K → K → K) (f1_d1 : K → K → K → K → K) (f1_d2 : K → K → K → K → K) (f1_d3 : K → K → K → K → K) (g00 : K → K → K → K → K) (g00_d1 : K → K → K → K → K) (g00_d11 : K → K → K → K → K) (g00_d12 : K → K → K → K → K) (g00_d13 : K → K → K → K → K) (g00_d2 : K → K → K → K → K) (g00_d22 : K → K → K → K → K) (g00_d23 : K → K → K → K → K) (g00_d3 : K → K → K → K → K) (g10 : K → K → K → K → K) (g10_d1 : K → K → K → K → K) (g10_d11 : K → K → K → K → K) (g10_d12 : K → K → K → K → K) (g10_d13 : K → K → K → K → K) (g10_d2 : K → K → K → K → K) (g10_d22 : K → K → K → K → K) (g10_d23 : K → K → K → K → K) (g10_d3 : K → K → K → K → K) (t y0 y1 a0 a1 b bu th thu v0 : K) :
    Gen.adj_gp_i_scalar_21_ng_out_0_5 g00 g00_d1 g00_d2 g00_d3 g10 g10_d1 g10_d2 g10_d3 t y0 y1 a0 a1 b bu th thu v0 = 0 := by
  simp [Gen.adj_gp_i_scalar_21_ng_out_0_5]

theorem adj_gp_i_scalar_21_ng_graph (f0 : K → K → K → K → K) (f0_d1 : K → K → K → K → K) (f0_d2 : K → K → K → K → K) (f0_d3 : K → K → K → K → K) (f1 : K → K → K → K → K) (f1_d1 : K → K → K → K → K) (f1_d2 : K → K → K → K → K) (f1_d3 : K → K → K → K → K) (g00 : K → K → K → K → K) (g00_d1 : K → K → K → K → K) (g00_d11 : K → K → K → K → K) (g00_d12 : K → K → K → K → K) (g00_d13 : K → K → K → K → K) (g00_d2 : K → K → K → K → K) (g00_d22 : K → K → K → K → K) (g00_d23 : K → K → K → K → K) (g00_d3 : K → K → K → K → K) (g10 : K → K → K → K → K) (g10_d1 : K → K → K → K → K) (g10_d11 : K → K → K → K → K) (g10_d12 : K → K → K → K → K) (g10_d13 : K → K → K → K → K) (g10_d2 : K → K → K → K → K) (g10_d22 : K → K → K → K → K) (g10_d23 : K → K → K → K → K) (g10_d3 : K → K → K → K → K) (t y0 y1 a0 a1 b bu th thu v0 : K) :
    Gen.adj_gp_i_scalar_21_ng_rg_out g00 g00_d1 g00_d2 g00_d3 g10 g10_d1 g10_d2 g10_d3 t y0 y1 a0 a1 b bu th thu v0 = 0 ∧
    Gen.adj_gp_i_scalar_21_ng_leaf_out g00 g00_d1 g00_d2 g00_d3 g10 g10_d1 g10_d2 g10_d3 t y0 y1 a0 a1 b bu th thu v0 = 1 ∧
    Gen.adj_gp_i_scalar_21_ng_rg_z_after g00 g00_d1 g00_d2 g00_d3 g10 g10_d1 g10_d2 g10_d3 t y0 y1 a0 a1 b bu th thu v0 = 0 ∧
    Gen.adj_gp_i_scalar_21_ng_leaf_z_after g00 g00_d1 g00_d2 g00_d3 g10 g10_d1 g10_d2 g10_d3 t y0 y1 a0 a1 b bu th thu v0 = 1 := by
  refine ⟨?_, ?_, ?_, ?_⟩ <;> simp only [Gen.adj_gp_i_scalar_21_ng_rg_out, Gen.adj_gp_i_scalar_21_ng_leaf_out, Gen.adj_gp_i_scalar_21_ng_rg_z_after, Gen.adj_gp_i_scalar_21_ng_leaf_z_after]

theorem adj_gp_i_scalar_21_en_spec (f0 : K → K → K → K → K) (f0_d1 : K → K → K → K → K) (f0_d2 : K → K → K → K → K) (f0_d3 : K → K → K → K → K) (f1 : K → K → K → K → K) (f1_d1 : K → K → K → K → K) (f1_d2 : K → K → K → K → K) (f1_d3 : K → K → K → K → K) (g00 : K → K → K → K → K) (g00_d1 : K → K → K → K → K) (g00_d11 : K → K → K → K → K) (g00_d12 : K → K → K → K → K) (g00_d13 : K → K → K → K → K) (g00_d2 : K → K → K → K → K) (g00_d22 : K → K → K → K → K) (g00_d23 : K → K → K → K → K) (g00_d3 : K → K → K → K → K) (g10 : K → K → K → K → K) (g10_d1 : K → K → K → K → K) (g10_d11 : K → K → K → K → K) (g10_d12 : K → K → K → K → K) (g10_d13 : K → K → K → K → K) (g10_d2 : K → K → K → K → K) (g10_d22 : K → K → K → K → K) (g10_d23 : K → K → K → K → K) (g10_d3 : K → K → K → K → K) (t y0 y1 a0 a1 b bu th thu v0 : K) :
    Gen.adj_gp_i_scalar_21_en_out_0_0 g00 g00_d1 g00_d2 g00_d3 g10 g10_d1 g10_d2 g10_d3 t y0 y1 a0 a1 b bu th thu v0
      = gProdY (jet_scalar_21 f0 f0_d1 f0_d2 f0_d3 f1 f1_d1 f1_d2 f1_d3 g00 g00_d1 g00_d11 g00_d12 g00_d13 g00_d2 g00_d22 g00_d23 g00_d3 g10 g10_d1 g10_d11 g10_d12 g10_d13 g10_d2 g10_d22 g10_d23 g10_d3 t y0 y1 th) ![v0] 0 ∧
    Gen.adj_gp_i_scalar_21_en_out_0_1 g00 g00_d1 g00_d2 g00_d3 g10 g10_d1 g10_d2 g10_d3 t y0 y1 a0 a1 b bu th thu v0
      = gProdY (jet_scalar_21 f0 f0_d1 f0_d2 f0_d3 f1 f1_d1 f1_d2 f1_d3 g00 g00_d1 g00_d11 g00_d12 g00_d13 g00_d2 g00_d22 g00_d23 g00_d3 g10 g10_d1 g10_d11 g10_d12 g10_d13 g10_d2 g10_d22 g10_d23 g10_d3 t y0 y1 th) ![v0] 1 ∧
    Gen.adj_gp_i_scalar_21_en_out_0_2 g00 g00_d1 g00_d2 g00_d3 g10 g10_d1 g10_d2 g10_d3 t y0 y1 a0 a1 b bu th thu v0
      = gProdA (jet_scalar_21 f0 f0_d1 f0_d2 f0_d3 f1 f1_d1 f1_d2 f1_d3 g00 g00_d1 g00_d11 g00_d12 g00_d13 g00_d2 g00_d22 g00_d23 g00_d3 g10 g10_d1 g10_d11 g10_d12 g10_d13 g10_d2 g10_d22 g10_d23 g10_d3 t y0 y1 th) ![a0, a1] ![v0] 0 ∧
    Gen.adj_gp_i_scalar_21_en_out_0_3 g00 g00_d1 g00_d2 g00_d3 g10 g10_d1 g10_d2 g10_d3 t y0 y1 a0 a1 b bu th thu v0
      = gProdA (jet_scalar_21 f0 f0_d1 f0_d2 f0_d3 f1 f1_d1 f1_d2 f1_d3 g00 g00_d1 g00_d11 g00_d12 g00_d13 g00_d2 g00_d22 g00_d23 g00_d3 g10 g10_d1 g10_d11 g10_d12 g10_d13 g10_d2 g10_d22 g10_d23 g10_d3 t y0 y1 th) ![a0, a1] ![v0] 1 ∧
    Gen.adj_gp_i_scalar_21_en_out_0_4 g00 g00_d1 g00_d2 g00_d3 g10 g10_d1 g10_d2 g10_d3 t y0 y1 a0 a1 b bu th thu v0
      = gProdTh (jet_scalar_21 f0 f0_d1 f0_d2 f0_d3 f1 f1_d1 f1_d2 f1_d3 g00 g00_d1 g00_d11 g00_d12 g00_d13 g00_d2 g00_d22 g00_d23 g00_d3 g10 g10_d1 g10_d11 g10_d12 g10_d13 g10_d2 g10_d22 g10_d23 g10_d3 t y0 y1 th) ![a0, a1] ![v0] 0 ∧
    Gen.adj_gp_i_scalar_21_en_out_0_5 g00 g00_d1 g00_d2 g00_d3 g10 g10_d1 g10_d2 g10_d3 t y0 y1 a0 a1 b bu th thu v0
      = gProdTh (jet_scalar_21 f0 f0_d1 f0_d2 f0_d3 f1 f1_d1 f1_d2 f1_d3 g00 g00_d1 g00_d11 g00_d12 g00_d13 g00_d2 g00_d22 g00_d23 g00_d3 g10 g10_d1 g10_d11 g10_d12 g10_d13 g10_d2 g10_d22 g10_d23 g10_d3 t y0 y1 th) ![a0, a1] ![v0] 1 := by
  refine ⟨?_, ?_, ?_, ?_, ?_, ?_⟩ <;>
  simp [Gen.adj_gp_i_scalar_21_en_out_0_0, Gen.adj_gp_i_scalar_21_en_out_0_1, Gen.adj_gp_i_scalar_21_en_out_0_2, Gen.adj_gp_i_scalar_21_en_out_0_3, Gen.adj_gp_i_scalar_21_en_out_0_4, Gen.adj_gp_i_scalar_21_en_out_0_5, jet_scalar_21, stratDriftY, stratDriftA, stratDriftTh, itoDriftY, itoDriftA, itoDriftTh, gProdY, gProdA, gProdTh, gdgY, gdgA, gdgTh, driftY, driftA, driftTh, diffY, diffA, diffTh, itoCorr, itoCorrY, itoCorrTh, fStrat, fStratY, fStratTh, colCorrY, colCorrA, colCorrTh, Fin.sum_univ_two, Fin.sum_univ_one, Fin.isValue, Matrix.cons_val_zero, Matrix.cons_val_one, Matrix.cons_val_fin_one, Matrix.head_cons] <;> ring

theorem adj_gp_i_scalar_21_en_unused_param_zero (f0 : K → K → K → K → K) (f0_d1 : K → K → K → K → K) (f0_d2 : K → K → K → K → K) (f0_d3 : K → K → K → K → K) (f1 : K → K → K → K → K) (f1_d1 : K → K → K → K → K) (f1_d2 : K → K → K → K → K) (f1_d3 : K → K → K → K → K) (g00 : K → K → K → K → K) (g00_d1 : K → K → K → K → K) (g00_d11 : K → K → K → K → K) (g00_d12 : K → K → K → K → K) (g00_d13 : K → K → K → K → K) (g00_d2 : K → K → K → K → K) (g00_d22 : K → K → K → K → K) (g00_d23 : K → K → K → K → K) (g00_d3 : K → K → K → K → K) (g10 : K → K → K → K → K) (g10_d1 : K → K → K → K → K) (g10_d11 : K → K → K → K → K) (g10_d12 : K → K → K → K → K) (g10_d13 : K → K → K → K → K) (g10_d2 : K → K → K → K → K) (g10_d22 : K → K → K → K → K) (g10_d23 : K → K → K → K → K) (g10_d3 : K → K → K → K → K) (t y0 y1 a0 a1 b bu th thu v0 : K) :
    Gen.adj_gp_i_scalar_21_en_out_0_5 g00 g00_d1 g00_d2 g00_d3 g10 g10_d1 g10_d2 g10_d3 t y0 y1 a0 a1 b bu th thu v0 = 0 := by
  simp [Gen.adj_gp_i_scalar_21_en_out_0_5]

theorem adj_gp_i_scalar_21_en_graph (f0 : K → K → K → K → K) (f0_d1 : K → K → K → K → K) (f0_d2 : K → K → K → K → K) (f0_d3 : K → K → K → K → K) (f1 : K → K → K → K → K) (f1_d1 : K → K → K → K → K) (f1_d2 : K → K → K → K → K) (f1_d3 : K → K → K → K → K) (g00 : K → K → K → K → K) (g00_d1 : K → K → K → K → K) (g00_d11 : K → K → K → K → K) (g00_d12 : K → K → K → K → K) (g00_d13 : K → K → K → K → K) (g00_d2 : K → K → K → K → K) (g00_d22 : K → K → K → K → K) (g00_d23 : K → K → K → K → K) (g00_d3 : K → K → K → K → K) (g10 : K → K → K → K → K) (g10_d1 : K → K → K → K → K) (g10_d11 : K → K → K → K → K) (g10_d12 : K → K → K → K → K) (g10_d13 : K → K → K → K → K) (g10_d2 : K → K → K → K → K) (g10_d22 : K → K → K → K → K) (g10_d23 : K → K → K → K → K) (g10_d3 : K → K → K → K → K) (t y0 y1 a0 a1 b bu th thu v0 : K) :
    Gen.adj_gp_i_scalar_21_en_rg_out g00 g00_d1 g00_d2 g00_d3 g10 g10_d1 g10_d2 g10_d3 t y0 y1 a0 a1 b bu th thu v0 = 1 ∧
    Gen.adj_gp_i_scalar_21_en_leaf_out g00 g00_d1 g00_d2 g00_d3 g10 g10_d1 g10_d2 g10_d3 t y0 y1 a0 a1 b bu th thu v0 = 0 ∧
    Gen.adj_gp_i_scalar_21_en_rg_z_after g00 g00_d1 g00_d2 g00_d3 g10 g10_d1 g10_d2 g10_d3 t y0 y1 a0 a1 b bu th thu v0 = 1 ∧
    Gen.adj_gp_i_scalar_21_en_leaf_z_after g00 g00_d1 g00_d2 g00_d3 g10 g10_d1 g10_d2 g10_d3 t y0 y1 a0 a1 b bu th thu v0 = 1 := by
  refine ⟨?_, ?_, ?_, ?_⟩ <;> simp only [Gen.adj_gp_i_scalar_21_en_rg_out, Gen.adj_gp_i_scalar_21_en_leaf_out, Gen.adj_gp_i_scalar_21_en_rg_z_after, Gen.adj_gp_i_scalar_21_en_leaf_z_after]

theorem adj_fgp_i_scalar_21_ng_unused_param_zero (f0 : K → K → K → K → K) (f0_d1 : K → K → K → K → K) (f0_d2 : K → K → K → K → K) (f0_d3 : K → K → K → K → K) (f1 : K → K → K → K → K) (f1_d1 : K → K → K → K → K) (f1_d2 : K → K → K → K → K) (f1_d3 : K → K → K → K → K) (g00 : K → K → K → K → K) (g00_d1 : K → K → K → K → K) (g00_d11 : K → K → K → K → K) (g00_d12 : K → K → K → K → K) (g00_d13 : K → K → K → K → K) (g00_d2 : K → K → K → K → K) (g00_d22 : K → K → K → K → K) (g00_d23 : K → K → K → K → K) (g00_d3 : K → K → K → K → K) (g10 : K → K → K → K → K) (g10_d1 : K → K → K → K → K) (g10_d11 : K → K → K → K → K) (g10_d12 : K → K → K → K → K) (g10_d13 : K → K → K → K → K) (g10_d2 : K → K → K → K → K) (g10_d22 : K → K → K → K → K) (g10_d23 : K → K → K → K → K) (g10_d3 : K → K → K → K → K) (t y0 y1 a0 a1 b bu th thu v0 : K) :
    Gen.adj_fgp_i_scalar_21_ng_f_0_5 f0 f0_d1 f0_d2 f0_d3 f1 f1_d1 f1_d2 f1_d3 g00 g00_d1 g00_d11 g00_d12 g00_d13 g00_d2 g00_d22 g00_d23 g00_d3 g10 g10_d1 g10_d11 g10_d12 g10_d13 g10_d2 g10_d22 g10_d23 g10_d3 t y0 y1 a0 a1 b bu th thu v0 = 0 ∧
    Gen.adj_fgp_i_scalar_21_ng_gp_0_5 f0 f0_d1 f0_d2 f0_d3 f1 f1_d1 f1_d2 f1_d3 g00 g00_d1 g00_d11 g00_d12 g00_d13 g00_d2 g00_d22 g00_d23 g00_d3 g10 g10_d1 g10_d11 g10_d12 g10_d13 g10_d2 g10_d22 g10_d23 g10_d3 t y0 y1 a0 a1 b bu th thu v0 = 0 := by
  refine ⟨?_, ?_⟩ <;> simp [Gen.adj_fgp_i_scalar_21_ng_f_0_5, Gen.adj_fgp_i_scalar_21_ng_gp_0_5]

theorem adj_fgp_i_scalar_21_ng_pair (f0 : K → K → K → K → K) (f0_d1 : K → K → K → K → K) (f0_d2 : K → K → K → K → K) (f0_d3 : K → K → K → K → K) (f1 : K → K → K → K → K) (f1_d1 : K → K → K → K → K) (f1_d2 : K → K → K → K → K) (f1_d3 : K → K → K → K → K) (g00 : K → K → K → K → K) (g00_d1 : K → K → K → K → K) (g00_d11 : K → K → K → K → K) (g00_d12 : K → K → K → K → K) (g00_d13 : K → K → K → K → K) (g00_d2 : K → K → K → K → K) (g00_d22 : K → K → K → K → K) (g00_d23 : K → K → K → K → K) (g00_d3 : K → K → K → K → K) (g10 : K → K → K → K → K) (g10_d1 : K → K → K → K → K) (g10_d11 : K → K → K → K → K) (g10_d12 : K → K → K → K → K) (g10_d13 : K → K → K → K → K) (g10_d2 : K → K → K → K → K) (g10_d22 : K → K → K → K → K) (g10_d23 : K → K → K → K → K) (g10_d3 : K → K → K → K → K) (t y0 y1 a0 a1 b bu th thu v0 : K) :
    Gen.adj_fgp_i_scalar_21_ng_f_0_0 f0 f0_d1 f0_d2 f0_d3 f1 f1_d1 f1_d2 f1_d3 g00 g00_d1 g00_d11 g00_d12 g00_d13 g00_d2 g00_d22 g00_d23 g00_d3 g10 g10_d1 g10_d11 g10_d12 g10_d13 g10_d2 g10_d22 g10_d23 g10_d3 t y0 y1 a0 a1 b bu th thu v0
      = Gen.adj_f_i_scalar_21_ng_out_0_0 f0 f0_d1 f0_d2 f0_d3 f1 f1_d1 f1_d2 f1_d3 g00 g00_d1 g00_d11 g00_d12 g00_d13 g00_d2 g00_d22 g00_d23 g00_d3 g10 g10_d1 g10_d11 g10_d12 g10_d13 g10_d2 g10_d22 g10_d23 g10_d3 t y0 y1 a0 a1 b bu th thu ∧
    Gen.adj_fgp_i_scalar_21_ng_f_0_1 f0 f0_d1 f0_d2 f0_d3 f1 f1_d1 f1_d2 f1_d3 g00 g00_d1 g00_d11 g00_d12 g00_d13 g00_d2 g00_d22 g00_d23 g00_d3 g10 g10_d1 g10_d11 g10_d12 g10_d13 g10_d2 g10_d22 g10_d23 g10_d3 t y0 y1 a0 a1 b bu th thu v0
      = Gen.adj_f_i_scalar_21_ng_out_0_1 f0 f0_d1 f0_d2 f0_d3 f1 f1_d1 f1_d2 f1_d3 g00 g00_d1 g00_d11 g00_d12 g00_d13 g00_d2 g00_d22 g00_d23 g00_d3 g10 g10_d1 g10_d11 g10_d12 g10_d13 g10_d2 g10_d22 g10_d23 g10_d3 t y0 y1 a0 a1 b bu th thu ∧
    Gen.adj_fgp_i_scalar_21_ng_f_0_2 f0 f0_d1 f0_d2 f0_d3 f1 f1_d1 f1_d2 f1_d3 g00 g00_d1 g00_d11 g00_d12 g00_d13 g00_d2 g00_d22 g00_d23 g00_d3 g10 g10_d1 g10_d11 g10_d12 g10_d13 g10_d2 g10_d22 g10_d23 g10_d3 t y0 y1 a0 a1 b bu th thu v0
      = Gen.adj_f_i_scalar_21_ng_out_0_2 f0 f0_d1 f0_d2 f0_d3 f1 f1_d1 f1_d2 f1_d3 g00 g00_d1 g00_d11 g00_d12 g00_d13 g00_d2 g00_d22 g00_d23 g00_d3 g10 g10_d1 g10_d11 g10_d12 g10_d13 g10_d2 g10_d22 g10_d23 g10_d3 t y0 y1 a0 a1 b bu th thu ∧
    Gen.adj_fgp_i_scalar_21_ng_f_0_3 f0 f0_d1 f0_d2 f0_d3 f1 f1_d1 f1_d2 f1_d3 g00 g00_d1 g00_d11 g00_d12 g00_d13 g00_d2 g00_d22 g00_d23 g00_d3 g10 g10_d1 g10_d11 g10_d12 g10_d13 g10_d2 g10_d22 g10_d23 g10_d3 t y0 y1 a0 a1 b bu th thu v0
      = Gen.adj_f_i_scalar_21_ng_out_0_3 f0 f0_d1 f0_d2 f0_d3 f1 f1_d1 f1_d2 f1_d3 g00 g00_d1 g00_d11 g00_d12 g00_d13 g00_d2 g00_d22 g00_d23 g00_d3 g10 g10_d1 g10_d11 g10_d12 g10_d13 g10_d2 g10_d22 g10_d23 g10_d3 t y0 y1 a0 a1 b bu th thu ∧
    Gen.adj_fgp_i_scalar_21_ng_f_0_4 f0 f0_d1 f0_d2 f0_d3 f1 f1_d1 f1_d2 f1_d3 g00 g00_d1 g00_d11 g00_d12 g00_d13 g00_d2 g00_d22 g00_d23 g00_d3 g10 g10_d1 g10_d11 g10_d12 g10_d13 g10_d2 g10_d22 g10_d23 g10_d3 t y0 y1 a0 a1 b bu th thu v0
      = Gen.adj_f_i_scalar_21_ng_out_0_4 f0 f0_d1 f0_d2 f0_d3 f1 f1_d1 f1_d2 f1_d3 g00 g00_d1 g00_d11 g00_d12 g00_d13 g00_d2 g00_d22 g00_d23 g00_d3 g10 g10_d1 g10_d11 g10_d12 g10_d13 g10_d2 g10_d22 g10_d23 g10_d3 t y0 y1 a0 a1 b bu th thu ∧
    Gen.adj_fgp_i_scalar_21_ng_f_0_5 f0 f0_d1 f0_d2 f0_d3 f1 f1_d1 f1_d2 f1_d3 g00 g00_d1 g00_d11 g00_d12 g00_d13 g00_d2 g00_d22 g00_d23 g00_d3 g10 g10_d1 g10_d11 g10_d12 g10_d13 g10_d2 g10_d22 g10_d23 g10_d3 t y0 y1 a0 a1 b bu th thu v0
      = Gen.adj_f_i_scalar_21_ng_out_0_5 f0 f0_d1 f0_d2 f0_d3 f1 f1_d1 f1_d2 f1_d3 g00 g00_d1 g00_d11 g00_d12 g00_d13 g00_d2 g00_d22 g00_d23 g00_d3 g10 g10_d1 g10_d11 g10_d12 g10_d13 g10_d2 g10_d22 g10_d23 g10_d3 t y0 y1 a0 a1 b bu th thu ∧
    Gen.adj_fgp_i_scalar_21_ng_gp_0_0 f0 f0_d1 f0_d2 f0_d3 f1 f1_d1 f1_d2 f1_d3 g00 g00_d1 g00_d11 g00_d12 g00_d13 g00_d2 g00_d22 g00_d23 g00_d3 g10 g10_d1 g10_d11 g10_d12 g10_d13 g10_d2 g10_d22 g10_d23 g10_d3 t y0 y1 a0 a1 b bu th thu v0
      = Gen.adj_gp_i_scalar_21_ng_out_0_0 g00 g00_d1 g00_d2 g00_d3 g10 g10_d1 g10_d2 g10_d3 t y0 y1 a0 a1 b bu th thu v0 ∧
    Gen.adj_fgp_i_scalar_21_ng_gp_0_1 f0 f0_d1 f0_d2 f0_d3 f1 f1_d1 f1_d2 f1_d3 g00 g00_d1 g00_d11 g00_d12 g00_d13 g00_d2 g00_d22 g00_d23 g00_d3 g10 g10_d1 g10_d11 g10_d12 g10_d13 g10_d2 g10_d22 g10_d23 g10_d3 t y0 y1 a0 a1 b bu th thu v0
      = Gen.adj_gp_i_scalar_21_ng_out_0_1 g00 g00_d1 g00_d2 g00_d3 g10 g10_d1 g10_d2 g10_d3 t y0 y1 a0 a1 b bu th thu v0 ∧
    Gen.adj_fgp_i_scalar_21_ng_gp_0_2 f0 f0_d1 f0_d2 f0_d3 f1 f1_d1 f1_d2 f1_d3 g00 g00_d1 g00_d11 g00_d12 g00_d13 g00_d2 g00_d22 g00_d23 g00_d3 g10 g10_d1 g10_d11 g10_d12 g10_d13 g10_d2 g10_d22 g10_d23 g10_d3 t y0 y1 a0 a1 b bu th thu v0
      = Gen.adj_gp_i_scalar_21_ng_out_0_2 g00 g00_d1 g00_d2 g00_d3 g10 g10_d1 g10_d2 g10_d3 t y0 y1 a0 a1 b bu th thu v0 ∧
    Gen.adj_fgp_i_scalar_21_ng_gp_0_3 f0 f0_d1 f0_d2 f0_d3 f1 f1_d1 f1_d2 f1_d3 g00 g00_d1 g00_d11 g00_d12 g00_d13 g00_d2 g00_d22 g00_d23 g00_d3 g10 g10_d1 g10_d11 g10_d12 g10_d13 g10_d2 g10_d22 g10_d23 g10_d3 t y0 y1 a0 a1 b bu th thu v0
      = Gen.adj_gp_i_scalar_21_ng_out_0_3 g00 g00_d1 g00_d2 g00_d3 g10 g10_d1 g10_d2 g10_d3 t y0 y1 a0 a1 b bu th thu v0 ∧
    Gen.adj_fgp_i_scalar_21_ng_gp_0_4 f0 f0_d1 f0_d2 f0_d3 f1 f1_d1 f1_d2 f1_d3 g00 g00_d1 g00_d11 g00_d12 g00_d13 g00_d2 g00_d22 g00_d23 g00_d3 g10 g10_d1 g10_d11 g10_d12 g10_d13 g10_d2 g10_d22 g10_d23 g10_d3 t y0 y1 a0 a1 b bu th thu v0
      = Gen.adj_gp_i_scalar_21_ng_out_0_4 g00 g00_d1 g00_d2 g00_d3 g10 g10_d1 g10_d2 g10_d3 t y0 y1 a0 a1 b bu th thu v0 ∧
    Gen.adj_fgp_i_scalar_21_ng_gp_0_5 f0 f0_d1 f0_d2 f0_d3 f1 f1_d1 f1_d2 f1_d3 g00 g00_d1 g00_d11 g00_d12 g00_d13 g00_d2 g00_d22 g00_d23 g00_d3 g10 g10_d1 g10_d11 g10_d12 g10_d13 g10_d2 g10_d22 g10_d23 g10_d3 t y0 y1 a0 a1 b bu th thu v0
      = Gen.adj_gp_i_scalar_21_ng_out_0_5 g00 g00_d1 g00_d2 g00_d3 g10 g10_d1 g10_d2 g10_d3 t y0 y1 a0 a1 b bu th thu v0 := by
  refine ⟨?_, ?_, ?_, ?_, ?_, ?_, ?_, ?_, ?_, ?_, ?_, ?_⟩ <;> simp only [Gen.adj_fgp_i_scalar_21_ng_f_0_0, Gen.adj_f_i_scalar_21_ng_out_0_0, Gen.adj_fgp_i_scalar_21_ng_f_0_1, Gen.adj_f_i_scalar_21_ng_out_0_1, Gen.adj_fgp_i_scalar_21_ng_f_0_2, Gen.adj_f_i_scalar_21_ng_out_0_2, Gen.adj_fgp_i_scalar_21_ng_f_0_3, Gen.adj_f_i_scalar_21_ng_out_0_3, Gen.adj_fgp_i_scalar_21_ng_f_0_4, Gen.adj_f_i_scalar_21_ng_out_0_4, Gen.adj_fgp_i_scalar_21_ng_f_0_5, Gen.adj_f_i_scalar_21_ng_out_0_5, Gen.adj_fgp_i_scalar_21_ng_gp_0_0, Gen.adj_gp_i_scalar_21_ng_out_0_0, Gen.adj_fgp_i_scalar_21_ng_gp_0_1, Gen.adj_gp_i_scalar_21_ng_out_0_1, Gen.adj_fgp_i_scalar_21_ng_gp_0_2, Gen.adj_gp_i_scalar_21_ng_out_0_2, Gen.adj_fgp_i_scalar_21_ng_gp_0_3, Gen.adj_gp_i_scalar_21_ng_out_0_3, Gen.adj_fgp_i_scalar_21_ng_gp_0_4, Gen.adj_gp_i_scalar_21_ng_out_0_4, Gen.adj_fgp_i_scalar_21_ng_gp_0_5, Gen.adj_gp_i_scalar_21_ng_out_0_5] <;> ring

theorem adj_fgp_i_scalar_21_ng_graph (f0 : K → K → K → K → K) (f0_d1 : K → K → K → K → K) (f0_d2 : K → K → K → K → K) (f0_d3 : K → K → K → K → K) (f1 : K → K → K → K → K) (f1_d1 : K → K → K → K → K) (f1_d2 : K → K → K → K → K) (f1_d3 : K → K → K → K → K) (g00 : K → K → K → K → K) (g00_d1 : K → K → K → K → K) (g00_d11 : K → K → K → K → K) (g00_d12 : K → K → K → K → K) (g00_d13 : K → K → K → K → K) (g00_d2 : K → K → K → K → K) (g00_d22 : K → K → K → K → K) (g00_d23 : K → K → K → K → K) (g00_d3 : K → K → K → K → K) (g10 : K → K → K → K → K) (g10_d1 : K → K → K → K → K) (g10_d11 : K → K → K → K → K) (g10_d12 : K → K → K → K → K) (g10_d13 : K → K → K → K → K) (g10_d2 : K → K → K → K → K) (g10_d22 : K → K → K → K → K) (g10_d23 : K → K → K → K → K) (g10_d3 : K → K → K → K → K) (t y0 y1 a0 a1 b bu th thu v0 : K) :
    Gen.adj_fgp_i_scalar_21_ng_rg_f f0 f0_d1 f0_d2 f0_d3 f1 f1_d1 f1_d2 f1_d3 g00 g00_d1 g00_d11 g00_d12 g00_d13 g00_d2 g00_d22 g00_d23 g00_d3 g10 g10_d1 g10_d11 g10_d12 g10_d13 g10_d2 g10_d22 g10_d23 g10_d3 t y0 y1 a0 a1 b bu th thu v0 = 0 ∧
    Gen.adj_fgp_i_scalar_21_ng_leaf_f f0 f0_d1 f0_d2 f0_d3 f1 f1_d1 f1_d2 f1_d3 g00 g00_d1 g00_d11 g00_d12 g00_d13 g00_d2 g00_d22 g00_d23 g00_d3 g10 g10_d1 g10_d11 g10_d12 g10_d13 g10_d2 g10_d22 g10_d23 g10_d3 t y0 y1 a0 a1 b bu th thu v0 = 1 ∧
    Gen.adj_fgp_i_scalar_21_ng_rg_gp f0 f0_d1 f0_d2 f0_d3 f1 f1_d1 f1_d2 f1_d3 g00 g00_d1 g00_d11 g00_d12 g00_d13 g00_d2 g00_d22 g00_d23 g00_d3 g10 g10_d1 g10_d11 g10_d12 g10_d13 g10_d2 g10_d22 g10_d23 g10_d3 t y0 y1 a0 a1 b bu th thu v0 = 0 ∧
    Gen.adj_fgp_i_scalar_21_ng_leaf_gp f0 f0_d1 f0_d2 f0_d3 f1 f1_d1 f1_d2 f1_d3 g00 g00_d1 g00_d11 g00_d12 g00_d13 g00_d2 g00_d22 g00_d23 g00_d3 g10 g10_d1 g10_d11 g10_d12 g10_d13 g10_d2 g10_d22 g10_d23 g10_d3 t y0 y1 a0 a1 b bu th thu v0 = 1 ∧
    Gen.adj_fgp_i_scalar_21_ng_rg_z_after f0 f0_d1 f0_d2 f0_d3 f1 f1_d1 f1_d2 f1_d3 g00 g00_d1 g00_d11 g00_d12 g00_d13 g00_d2 g00_d22 g00_d23 g00_d3 g10 g10_d1 g10_d11 g10_d12 g10_d13 g10_d2 g10_d22 g10_d23 g10_d3 t y0 y1 a0 a1 b bu th thu v0 = 0 ∧
    Gen.adj_fgp_i_scalar_21_ng_leaf_z_after f0 f0_d1 f0_d2 f0_d3 f1 f1_d1 f1_d2 f1_d3 g00 g00_d1 g00_d11 g00_d12 g00_d13 g00_d2 g00_d22 g00_d23 g00_d3 g10 g10_d1 g10_d11 g10_d12 g10_d13 g10_d2 g10_d22 g10_d23 g10_d3 t y0 y1 a0 a1 b bu th thu v0 = 1 := by
  refine ⟨?_, ?_, ?_, ?_, ?_, ?_⟩ <;> simp only [Gen.adj_fgp_i_scalar_21_ng_rg_f, Gen.adj_fgp_i_scalar_21_ng_leaf_f, Gen.adj_fgp_i_scalar_21_ng_rg_gp, Gen.adj_fgp_i_scalar_21_ng_leaf_gp, Gen.adj_fgp_i_scalar_21_ng_rg_z_after, Gen.adj_fgp_i_scalar_21_ng_leaf_z_after]

theorem adj_fgp_i_scalar_21_en_unused_param_zero (f0 : K → K → K → K → K) (f0_d1 : K → K → K → K → K) (f0_d2 : K → K → K → K → K) (f0_d3 : K → K → K → K → K) (f1 : K → K → K → K → K) (f1_d1 : K → K → K → K → K) (f1_d2 : K → K → K → K → K) (f1_d3 : K → K → K → K → K) (g00 : K → K → K → K → K) (g00_d1 : K → K → K → K → K) (g00_d11 : K → K → K → K → K) (g00_d12 : K → K → K → K → K) (g00_d13 : K → K → K → K → K) (g00_d2 : K → K → K → K → K) (g00_d22 : K → K → K → K → K) (g00_d23 : K → K → K → K → K) (g00_d3 : K → K → K → K → K) (g10 : K → K → K → K → K) (g10_d1 : K → K → K → K → K) (g10_d11 : K → K → K → K → K) (g10_d12 : K → K → K → K → K) (g10_d13 : K → K → K → K → K) (g10_d2 : K → K → K → K → K) (g10_d22 : K → K → K → K → K) (g10_d23 : K → K → K → K → K) (g10_d3 : K → K → K → K → K) (t y0 y1 a0 a1 b bu th thu v0 : K) :
    Gen.adj_fgp_i_scalar_21_en_f_0_5 f0 f0_d1 f0_d2 f0_d3 f1 f1_d1 f1_d2 f1_d3 g00 g00_d1 g00_d11 g00_d12 g00_d13 g00_d2 g00_d22 g00_d23 g00_d3 g10 g10_d1 g10_d11 g10_d12 g10_d13 g10_d2 g10_d22 g10_d23 g10_d3 t y0 y1 a0 a1 b bu th thu v0 = 0 ∧
    Gen.adj_fgp_i_scalar_21_en_gp_0_5 f0 f0_d1 f0_d2 f0_d3 f1 f1_d1 f1_d2 f1_d3 g00 g00_d1 g00_d11 g00_d12 g00_d13 g00_d2 g00_d22 g00_d23 g00_d3 g10 g10_d1 g10_d11 g10_d12 g10_d13 g10_d2 g10_d22 g10_d23 g10_d3 t y0 y1 a0 a1 b bu th thu v0 = 0 := by
  refine ⟨?_, ?_⟩ <;> simp [Gen.adj_fgp_i_scalar_21_en_f_0_5, Gen.adj_fgp_i_scalar_21_en_gp_0_5]

theorem adj_fgp_i_scalar_21_en_pair (f0 : K → K → K → K → K) (f0_d1 : K → K → K → K → K) (f0_d2 : K → K → K → K → K) (f0_d3 : K → K → K → K → K) (f1 : K → K → K → K → K) (f1_d1 : K → K → K → K → K) (f1_d2 : K → K → K → K → K) (f1_d3 : K → K → K → K → K) (g00 : K → K → K → K → K) (g00_d1 : K → K → K → K → K) (g00_d11 : K → K → K → K → K) (g00_d12 : K → K → K → K → K) (g00_d13 : K → K → K → K → K) (g00_d2 : K → K → K → K → K) (g00_d22 : K → K → K → K → K) (g00_d23 : K → K → K → K → K) (g00_d3 : K → K → K → K → K) (g10 : K → K → K → K → K) (g10_d1 : K → K → K → K → K) (g10_d11 : K → K → K → K → K) (g10_d12 : K → K → K → K → K) (g10_d13 : K → K → K → K → K) (g10_d2 : K → K → K → K → K) (g10_d22 : K → K → K → K → K) (g10_d23 : K → K → K → K → K) (g10_d3 : K → K → K → K → K) (t y0 y1 a0 a1 b bu th thu v0 : K) :
    Gen.adj_fgp_i_scalar_21_en_f_0_0 f0 f0_d1 f0_d2 f0_d3 f1 f1_d1 f1_d2 f1_d3 g00 g00_d1 g00_d11 g00_d12 g00_d13 g00_d2 g00_d22 g00_d23 g00_d3 g10 g10_d1 g10_d11 g10_d12 g10_d13 g10_d2 g10_d22 g10_d23 g10_d3 t y0 y1 a0 a1 b bu th thu v0
      = Gen.adj_f_i_scalar_21_en_out_0_0 f0 f0_d1 f0_d2 f0_d3 f1 f1_d1 f1_d2 f1_d3 g00 g00_d1 g00_d11 g00_d12 g00_d13 g00_d2 g00_d22 g00_d23 g00_d3 g10 g10_d1 g10_d11 g10_d12 g10_d13 g10_d2 g10_d22 g10_d23 g10_d3 t y0 y1 a0 a1 b bu th thu ∧
    Gen.adj_fgp_i_scalar_21_en_f_0_1 f0 f0_d1 f0_d2 f0_d3 f1 f1_d1 f1_d2 f1_d3 g00 g00_d1 g00_d11 g00_d12 g00_d13 g00_d2 g00_d22 g00_d23 g00_d3 g10 g10_d1 g10_d11 g10_d12 g10_d13 g10_d2 g10_d22 g10_d23 g10_d3 t y0 y1 a0 a1 b bu th thu v0
      = Gen.adj_f_i_scalar_21_en_out_0_1 f0 f0_d1 f0_d2 f0_d3 f1 f1_d1 f1_d2 f1_d3 g00 g00_d1 g00_d11 g00_d12 g00_d13 g00_d2 g00_d22 g00_d23 g00_d3 g10 g10_d1 g10_d11 g10_d12 g10_d13 g10_d2 g10_d22 g10_d23 g10_d3 t y0 y1 a0 a1 b bu th thu ∧
    Gen.adj_fgp_i_scalar_21_en_f_0_2 f0 f0_d1 f0_d2 f0_d3 f1 f1_d1 f1_d2 f1_d3 g00 g00_d1 g00_d11 g00_d12 g00_d13 g00_d2 g00_d22 g00_d23 g00_d3 g10 g10_d1 g10_d11 g10_d12 g10_d13 g10_d2 g10_d22 g10_d23 g10_d3 t y0 y1 a0 a1 b bu th thu v0
      = Gen.adj_f_i_scalar_21_en_out_0_2 f0 f0_d1 f0_d2 f0_d3 f1 f1_d1 f1_d2 f1_d3 g00 g00_d1 g00_d11 g00_d12 g00_d13 g00_d2 g00_d22 g00_d23 g00_d3 g10 g10_d1 g10_d11 g10_d12 g10_d13 g10_d2 g10_d22 g10_d23 g10_d3 t y0 y1 a0 a1 b bu th thu ∧
    Gen.adj_fgp_i_scalar_21_en_f_0_3 f0 f0_d1 f0_d2 f0_d3 f1 f1_d1 f1_d2 f1_d3 g00 g00_d1 g00_d11 g00_d12 g00_d13 g00_d2 g00_d22 g00_d23 g00_d3 g10 g10_d1 g10_d11 g10_d12 g10_d13 g10_d2 g10_d22 g10_d23 g10_d3 t y0 y1 a0 a1 b bu th thu v0
      = Gen.adj_f_i_scalar_21_en_out_0_3 f0 f0_d1 f0_d2 f0_d3 f1 f1_d1 f1_d2 f1_d3 g00 g00_d1 g00_d11 g00_d12 g00_d13 g00_d2 g00_d22 g00_d23 g00_d3 g10 g10_d1 g10_d11 g10_d12 g10_d13 g10_d2 g10_d22 g10_d23 g10_d3 t y0 y1 a0 a1 b bu th thu ∧
    Gen.adj_fgp_i_scalar_21_en_f_0_4 f0 f0_d1 f0_d2 f0_d3 f1 f1_d1 f1_d2 f1_d3 g00 g00_d1 g00_d11 g00_d12 g00_d13 g00_d2 g00_d22 g00_d23 g00_d3 g10 g10_d1 g10_d11 g10_d12 g10_d13 g10_d2 g10_d22 g10_d23 g10_d3 t y0 y1 a0 a1 b bu th thu v0
      = Gen.adj_f_i_scalar_21_en_out_0_4 f0 f0_d1 f0_d2 f0_d3 f1 f1_d1 f1_d2 f1_d3 g00 g00_d1 g00_d11 g00_d12 g00_d13 g00_d2 g00_d22 g00_d23 g00_d3 g10 g10_d1 g10_d11 g10_d12 g10_d13 g10_d2 g10_d22 g10_d23 g10_d3 t y0 y1 a0 a1 b bu th thu ∧
    Gen.adj_fgp_i_scalar_21_en_f_0_5 f0 f0_d1 f0_d2 f0_d3 f1 f1_d1 f1_d2 f1_d3 g00 g00_d1 g00_d11 g00_d12 g00_d13 g00_d2 g00_d22 g00_d23 g00_d3 g10 g10_d1 g10_d11 g10_d12 g10_d13 g10_d2 g10_d22 g10_d23 g10_d3 t y0 y1 a0 a1 b bu th thu v0
      = Gen.adj_f_i_scalar_21_en_out_0_5 f0 f0_d1 f0_d2 f0_d3 f1 f1_d1 f1_d2 f1_d3 g00 g00_d1 g00_d11 g00_d12 g00_d13 g00_d2 g00_d22 g00_d23 g00_d3 g10 g10_d1 g10_d11 g10_d12 g10_d13 g10_d2 g10_d22 g10_d23 g10_d3 t y0 y1 a0 a1 b bu th thu ∧
    Gen.adj_fgp_i_scalar_21_en_gp_0_0 f0 f0_d1 f0_d2 f0_d3 f1 f1_d1 f1_d2 f1_d3 g00 g00_d1 g00_d11 g00_d12 g00_d13 g00_d2 g00_d22 g00_d23 g00_d3 g10 g10_d1 g10_d11 g10_d12 g10_d13 g10_d2 g10_d22 g10_d23 g10_d3 t y0 y1 a0 a1 b bu th thu v0
      = Gen.adj_gp_i_scalar_21_en_out_0_0 g00 g00_d1 g00_d2 g00_d3 g10 g10_d1 g10_d2 g10_d3 t y0 y1 a0 a1 b bu th thu v0 ∧
    Gen.adj_fgp_i_scalar_21_en_gp_0_1 f0 f0_d1 f0_d2 f0_d3 f1 f1_d1 f1_d2 f1_d3 g00 g00_d1 g00_d11 g00_d12 g00_d13 g00_d2 g00_d22 g00_d23 g00_d3 g10 g10_d1 g10_d11 g10_d12 g10_d13 g10_d2 g10_d22 g10_d23 g10_d3 t y0 y1 a0 a1 b bu th thu v0
      = Gen.adj_gp_i_scalar_21_en_out_0_1 g00 g00_d1 g00_d2 g00_d3 g10 g10_d1 g10_d2 g10_d3 t y0 y1 a0 a1 b bu th thu v0 ∧
    Gen.adj_fgp_i_scalar_21_en_gp_0_2 f0 f0_d1 f0_d2 f0_d3 f1 f1_d1 f1_d2 f1_d3 g00 g00_d1 g00_d11 g00_d12 g00_d13 g00_d2 g00_d22 g00_d23 g00_d3 g10 g10_d1 g10_d11 g10_d12 g10_d13 g10_d2 g10_d22 g10_d23 g10_d3 t y0 y1 a0 a1 b bu th thu v0
      = Gen.adj_gp_i_scalar_21_en_out_0_2 g00 g00_d1 g00_d2 g00_d3 g10 g10_d1 g10_d2 g10_d3 t y0 y1 a0 a1 b bu th thu v0 ∧
    Gen.adj_fgp_i_scalar_21_en_gp_0_3 f0 f0_d1 f0_d2 f0_d3 f1 f1_d1 f1_d2 f1_d3 g00 g00_d1 g00_d11 g00_d12 g00_d13 g00_d2 g00_d22 g00_d23 g00_d3 g10 g10_d1 g10_d11 g10_d12 g10_d13 g10_d2 g10_d22 g10_d23 g10_d3 t y0 y1 a0 a1 b bu th thu v0
      = Gen.adj_gp_i_scalar_21_en_out_0_3 g00 g00_d1 g00_d2 g00_d3 g10 g10_d1 g10_d2 g10_d3 t y0 y1 a0 a1 b bu th thu v0 ∧
    Gen.adj_fgp_i_scalar_21_en_gp_0_4 f0 f0_d1 f0_d2 f0_d3 f1 f1_d1 f1_d2 f1_d3 g00 g00_d1 g00_d11 g00_d12 g00_d13 g00_d2 g00_d22 g00_d23 g00_d3 g10 g10_d1 g10_d11 g10_d12 g10_d13 g10_d2 g10_d22 g10_d23 g10_d3 t y0 y1 a0 a1 b bu th thu v0
      = Gen.adj_gp_i_scalar_21_en_out_0_4 g00 g00_d1 g00_d2 g00_d3 g10 g10_d1 g10_d2 g10_d3 t y0 y1 a0 a1 b bu th thu v0 ∧
    Gen.adj_fgp_i_scalar_21_en_gp_0_5 f0 f0_d1 f0_d2 f0_d3 f1 f1_d1 f1_d2 f1_d3 g00 g00_d1 g00_d11 g00_d12 g00_d13 g00_d2 g00_d22 g00_d23 g00_d3 g10 g10_d1 g10_d11 g10_d12 g10_d13 g10_d2 g10_d22 g10_d23 g10_d3 t y0 y1 a0 a1 b bu th thu v0
      = Gen.adj_gp_i_scalar_21_en_out_0_5 g00 g00_d1 g00_d2 g00_d3 g10 g10_d1 g10_d2 g10_d3 t y0 y1 a0 a1 b bu th thu v0 := by
  refine ⟨?_, ?_, ?_, ?_, ?_, ?_, ?_, ?_, ?_, ?_, ?_, ?_⟩ <;> simp only [Gen.adj_fgp_i_scalar_21_en_f_0_0, Gen.adj_f_i_scalar_21_en_out_0_0, Gen.adj_fgp_i_scalar_21_en_f_0_1, Gen.adj_f_i_scalar_21_en_out_0_1, Gen.adj_fgp_i_scalar_21_en_f_0_2, Gen.adj_f_i_scalar_21_en_out_0_2, Gen.adj_fgp_i_scalar_21_en_f_0_3, Gen.adj_f_i_scalar_21_en_out_0_3, Gen.adj_fgp_i_scalar_21_en_f_0_4, Gen.adj_f_i_scalar_21_en_out_0_4, Gen.adj_fgp_i_scalar_21_en_f_0_5, Gen.adj_f_i_scalar_21_en_out_0_5, Gen.adj_fgp_i_scalar_21_en_gp_0_0, Gen.adj_gp_i_scalar_21_en_out_0_0, Gen.adj_fgp_i_scalar_21_en_gp_0_1, Gen.adj_gp_i_scalar_21_en_out_0_1, Gen.adj_fgp_i_scalar_21_en_gp_0_2, Gen.adj_gp_i_scalar_21_en_out_0_2, Gen.adj_fgp_i_scalar_21_en_gp_0_3, Gen.adj_gp_i_scalar_21_en_out_0_3, Gen.adj_fgp_i_scalar_21_en_gp_0_4, Gen.adj_gp_i_scalar_21_en_out_0_4, Gen.adj_fgp_i_scalar_21_en_gp_0_5, Gen.adj_gp_i_scalar_21_en_out_0_5] <;> ring

theorem adj_fgp_i_scalar_21_en_graph (f0 : K → K → K → K → K) (f0_d1 : K → K → K → K → K) (f0_d2 : K → K → K → K → K) (f0_d3 : K → K → K → K → K) (f1 : K → K → K → K → K) (f1_d1 : K → K → K → K → K) (f1_d2 : K → K → K → K → K) (f1_d3 : K → K → K → K → K) (g00 : K → K → K → K → K) (g00_d1 : K → K → K → K → K) (g00_d11 : K → K → K → K → K) (g00_d12 : K → K → K → K → K) (g00_d13 : K → K → K → K → K) (g00_d2 : K → K → K → K → K) (g00_d22 : K → K → K → K → K) (g00_d23 : K → K → K → K → K) (g00_d3 : K → K → K → K → K) (g10 : K → K → K → K → K) (g10_d1 : K → K → K → K → K) (g10_d11 : K → K → K → K → K) (g10_d12 : K → K → K → K → K) (g10_d13 : K → K → K → K → K) (g10_d2 : K → K → K → K → K) (g10_d22 : K → K → K → K → K) (g10_d23 : K → K → K → K → K) (g10_d3 : K → K → K → K → K) (t y0 y1 a0 a1 b bu th thu v0 : K) :
    Gen.adj_fgp_i_scalar_21_en_rg_f f0 f0_d1 f0_d2 f0_d3 f1 f1_d1 f1_d2 f1_d3 g00 g00_d1 g00_d11 g00_d12 g00_d13 g00_d2 g00_d22 g00_d23 g00_d3 g10 g10_d1 g10_d11 g10_d12 g10_d13 g10_d2 g10_d22 g10_d23 g10_d3 t y0 y1 a0 a1 b bu th thu v0 = 1 ∧
    Gen.adj_fgp_i_scalar_21_en_leaf_f f0 f0_d1 f0_d2 f0_d3 f1 f1_d1 f1_d2 f1_d3 g00 g00_d1 g00_d11 g00_d12 g00_d13 g00_d2 g00_d22 g00_d23 g00_d3 g10 g10_d1 g10_d11 g10_d12 g10_d13 g10_d2 g10_d22 g10_d23 g10_d3 t y0 y1 a0 a1 b bu th thu v0 = 0 ∧
    Gen.adj_fgp_i_scalar_21_en_rg_gp f0 f0_d1 f0_d2 f0_d3 f1 f1_d1 f1_d2 f1_d3 g00 g00_d1 g00_d11 g00_d12 g00_d13 g00_d2 g00_d22 g00_d23 g00_d3 g10 g10_d1 g10_d11 g10_d12 g10_d13 g10_d2 g10_d22 g10_d23 g10_d3 t y0 y1 a0 a1 b bu th thu v0 = 1 ∧
    Gen.adj_fgp_i_scalar_21_en_leaf_gp f0 f0_d1 f0_d2 f0_d3 f1 f1_d1 f1_d2 f1_d3 g00 g00_d1 g00_d11 g00_d12 g00_d13 g00_d2 g00_d22 g00_d23 g00_d3 g10 g10_d1 g10_d11 g10_d12 g10_d13 g10_d2 g10_d22 g10_d23 g10_d3 t y0 y1 a0 a1 b bu th thu v0 = 0 ∧
    Gen.adj_fgp_i_scalar_21_en_rg_z_after f0 f0_d1 f0_d2 f0_d3 f1 f1_d1 f1_d2 f1_d3 g00 g00_d1 g00_d11 g00_d12 g00_d13 g00_d2 g00_d22 g00_d23 g00_d3 g10 g10_d1 g10_d11 g10_d12 g10_d13 g10_d2 g10_d22 g10_d23 g10_d3 t y0 y1 a0 a1 b bu th thu v0 = 1 ∧
    Gen.adj_fgp_i_scalar_21_en_leaf_z_after f0 f0_d1 f0_d2 f0_d3 f1 f1_d1 f1_d2 f1_d3 g00 g00_d1 g00_d11 g00_d12 g00_d13 g00_d2 g00_d22 g00_d23 g00_d3 g10 g10_d1 g10_d11 g10_d12 g10_d13 g10_d2 g10_d22 g10_d23 g10_d3 t y0 y1 a0 a1 b bu th thu v0 = 1 := by
  refine ⟨?_, ?_, ?_, ?_, ?_, ?_⟩ <;> simp only [Gen.adj_fgp_i_scalar_21_en_rg_f, Gen.adj_fgp_i_scalar_21_en_leaf_f, Gen.adj_fgp_i_scalar_21_en_rg_gp, Gen.adj_fgp_i_scalar_21_en_leaf_gp, Gen.adj_fgp_i_scalar_21_en_rg_z_after, Gen.adj_fgp_i_scalar_21_en_leaf_z_after]

theorem adj_f_i_general_11_ng_spec (f : K → K → K → K) (f_d1 : K → K → K → K) (f_d2 : K → K → K → K) (g : K → K → K → K) (g_d1 : K → K → K → K) (g_d11 : K → K → K → K) (g_d12 : K → K → K → K) (g_d2 : K → K → K → K) (t y0 a0 b bu th thu : K) :
    Gen.adj_f_i_general_11_ng_out_0_0 f f_d1 f_d2 g g_d1 g_d11 g_d12 g_d2 t y0 a0 b bu th thu
      = itoDriftY (jet_general_11 f f_d1 f_d2 g g_d1 g_d11 g_d12 g_d2 t y0 th) 0 ∧
    Gen.adj_f_i_general_11_ng_out_0_1 f f_d1 f_d2 g g_d1 g_d11 g_d12 g_d2 t y0 a0 b bu th thu
      = itoDriftA (jet_general_11 f f_d1 f_d2 g g_d1 g_d11 g_d12 g_d2 t y0 th) ![a0] 0 ∧
    Gen.adj_f_i_general_11_ng_out_0_2 f f_d1 f_d2 g g_d1 g_d11 g_d12 g_d2 t y0 a0 b bu th thu
      = itoDriftTh (jet_general_11 f f_d1 f_d2 g g_d1 g_d11 g_d12 g_d2 t y0 th) ![a0] 0 ∧
    Gen.adj_f_i_general_11_ng_out_0_3 f f_d1 f_d2 g g_d1 g_d11 g_d12 g_d2 t y0 a0 b bu th thu
      = itoDriftTh (jet_general_11 f f_d1 f_d2 g g_d1 g_d11 g_d12 g_d2 t y0 th) ![a0] 1 := by
  refine ⟨?_, ?_, ?_, ?_⟩ <;>
  simp [Gen.adj_f_i_general_11_ng_out_0_0, Gen.adj_f_i_general_11_ng_out_0_1, Gen.adj_f_i_general_11_ng_out_0_2, Gen.adj_f_i_general_11_ng_out_0_3, jet_general_11, stratDriftY, stratDriftA, stratDriftTh, itoDriftY, itoDriftA, itoDriftTh, gProdY, gProdA, gProdTh, gdgY, gdgA, gdgTh, driftY, driftA, driftTh, diffY, diffA, diffTh, itoCorr, itoCorrY, itoCorrTh, fStrat, fStratY, fStratTh, colCorrY, colCorrA, colCorrTh, Fin.sum_univ_two, Fin.sum_univ_one, Fin.isValue, Matrix.cons_val_zero, Matrix.cons_val_one, Matrix.cons_val_fin_one, Matrix.head_cons] <;> ring

theorem adj_f_i_general_11_ng_unused_param_zero (f : K → K → K → K) (f_d1 : K → K → K → K) (f_d2 : K → K → K → K) (g : K → K → K → K) (g_d1 : K → K → K → K) (g_d11 : K → K → K → K) (g_d12 : K → K → K → K) (g_d2 : K → K → K → K) (t y0 a0 b bu th thu : K) :
    Gen.adj_f_i_general_11_ng_out_0_3 f f_d1 f_d2 g g_d1 g_d11 g_d12 g_d2 t y0 a0 b bu th thu = 0 := by
  simp [Gen.adj_f_i_general_11_ng_out_0_3]

theorem adj_f_i_general_11_ng_graph (f : K → K → K → K) (f_d1 : K → K → K → K) (f_d2 : K → K → K → K) (g : K → K → K → K) (g_d1 : K → K → K → K) (g_d11 : K → K → K → K) (g_d12 : K → K → K → K) (g_d2 : K → K → K → K) (t y0 a0 b bu th thu : K) :
    Gen.adj_f_i_general_11_ng_rg_out f f_d1 f_d2 g g_d1 g_d11 g_d12 g_d2 t y0 a0 b bu th thu = 0 ∧
    Gen.adj_f_i_general_11_ng_leaf_out f f_d1 f_d2 g g_d1 g_d11 g_d12 g_d2 t y0 a0 b bu th thu = 1 ∧
    Gen.adj_f_i_general_11_ng_rg_z_after f f_d1 f_d2 g g_d1 g_d11 g_d12 g_d2 t y0 a0 b bu th thu = 0 ∧
    Gen.adj_f_i_general_11_ng_leaf_z_after f f_d1 f_d2 g g_d1 g_d11 g_d12 g_d2 t y0 a0 b bu th thu = 1 := by
  refine ⟨?_, ?_, ?_, ?_⟩ <;> simp only [Gen.adj_f_i_general_11_ng_rg_out, Gen.adj_f_i_general_11_ng_leaf_out, Gen.adj_f_i_general_11_ng_rg_z_after, Gen.adj_f_i_general_11_ng_leaf_z_after]

theorem adj_f_i_general_11_en_spec (f : K → K → K → K) (f_d1 : K → K → K → K) (f_d11 : K → K → K → K) (f_d12 : K → K → K → K) (f_d2 : K → K → K → K) (f_d22 : K → K → K → K) (g : K → K → K → K) (g_d1 : K → K → K → K) (g_d11 : K → K → K → K) (g_d111 : K → K → K → K) (g_d112 : K → K → K → K) (g_d12 : K → K → K → K) (g_d122 : K → K → K → K) (g_d2 : K → K → K → K) (g_d22 : K → K → K → K) (t y0 a0 b bu th thu : K) :
    Gen.adj_f_i_general_11_en_out_0_0 f f_d1 f_d11 f_d12 f_d2 f_d22 g g_d1 g_d11 g_d111 g_d112 g_d12 g_d122 g_d2 g_d22 t y0 a0 b bu th thu
      = itoDriftY (jet_general_11 f f_d1 f_d2 g g_d1 g_d11 g_d12 g_d2 t y0 th) 0 ∧
    Gen.adj_f_i_general_11_en_out_0_1 f f_d1 f_d11 f_d12 f_d2 f_d22 g g_d1 g_d11 g_d111 g_d112 g_d12 g_d122 g_d2 g_d22 t y0 a0 b bu th thu
      = itoDriftA (jet_general_11 f f_d1 f_d2 g g_d1 g_d11 g_d12 g_d2 t y0 th) ![a0] 0 ∧
    Gen.adj_f_i_general_11_en_out_0_2 f f_d1 f_d11 f_d12 f_d2 f_d22 g g_d1 g_d11 g_d111 g_d112 g_d12 g_d122 g_d2 g_d22 t y0 a0 b bu th thu
      = itoDriftTh (jet_general_11 f f_d1 f_d2 g g_d1 g_d11 g_d12 g_d2 t y0 th) ![a0] 0 ∧
    Gen.adj_f_i_general_11_en_out_0_3 f f_d1 f_d11 f_d12 f_d2 f_d22 g g_d1 g_d11 g_d111 g_d112 g_d12 g_d122 g_d2 g_d22 t y0 a0 b bu th thu
      = itoDriftTh (jet_general_11 f f_d1 f_d2 g g_d1 g_d11 g_d12 g_d2 t y0 th) ![a0] 1 := by
  refine ⟨?_, ?_, ?_, ?_⟩ <;>
  simp [Gen.adj_f_i_general_11_en_out_0_0, Gen.adj_f_i_general_11_en_out_0_1, Gen.adj_f_i_general_11_en_out_0_2, Gen.adj_f_i_general_11_en_out_0_3, jet_general_11, stratDriftY, stratDriftA, stratDriftTh, itoDriftY, itoDriftA, itoDriftTh, gProdY, gProdA, gProdTh, gdgY, gdgA, gdgTh, driftY, driftA, driftTh, diffY, diffA, diffTh, itoCorr, itoCorrY, itoCorrTh, fStrat, fStratY, fStratTh, colCorrY, colCorrA, colCorrTh, Fin.sum_univ_two, Fin.sum_univ_one, Fin.isValue, Matrix.cons_val_zero, Matrix.cons_val_one, Matrix.cons_val_fin_one, Matrix.head_cons] <;> ring

theorem adj_f_i_general_11_en_unused_param_zero (f : K → K → K → K) (f_d1 : K → K → K → K) (f_d11 : K → K → K → K) (f_d12 : K → K → K → K) (f_d2 : K → K → K → K) (f_d22 : K → K → K → K) (g : K → K → K → K) (g_d1 : K → K → K → K) (g_d11 : K → K → K → K) (g_d111 : K → K → K → K) (g_d112 : K → K → K → K) (g_d12 : K → K → K → K) (g_d122 : K → K → K → K) (g_d2 : K → K → K → K) (g_d22 : K → K → K → K) (t y0 a0 b bu th thu : K) :
    Gen.adj_f_i_general_11_en_out_0_3 f f_d1 f_d11 f_d12 f_d2 f_d22 g g_d1 g_d11 g_d111 g_d112 g_d12 g_d122 g_d2 g_d22 t y0 a0 b bu th thu = 0 := by
  simp [Gen.adj_f_i_general_11_en_out_0_3]

theorem adj_f_i_general_11_en_graph (f : K → K → K → K) (f_d1 : K → K → K → K) (f_d11 : K → K → K → K) (f_d12 : K → K → K → K) (f_d2 : K → K → K → K) (f_d22 : K → K → K → K) (g : K → K → K → K) (g_d1 : K → K → K → K) (g_d11 : K → K → K → K) (g_d111 : K → K → K → K) (g_d112 : K → K → K → K) (g_d12 : K → K → K → K) (g_d122 : K → K → K → K) (g_d2 : K → K → K → K) (g_d22 : K → K → K → K) (t y0 a0 b bu th thu : K) :
    Gen.adj_f_i_general_11_en_rg_out f f_d1 f_d11 f_d12 f_d2 f_d22 g g_d1 g_d11 g_d111 g_d112 g_d12 g_d122 g_d2 g_d22 t y0 a0 b bu th thu = 1 ∧
    Gen.adj_f_i_general_11_en_leaf_out f f_d1 f_d11 f_d12 f_d2 f_d22 g g_d1 g_d11 g_d111 g_d112 g_d12 g_d122 g_d2 g_d22 t y0 a0 b bu th thu = 0 ∧
    Gen.adj_f_i_general_11_en_rg_z_after f f_d1 f_d11 f_d12 f_d2 f_d22 g g_d1 g_d11 g_d111 g_d112 g_d12 g_d122 g_d2 g_d22 t y0 a0 b bu th thu = 1 ∧
    Gen.adj_f_i_general_11_en_leaf_z_after f f_d1 f_d11 f_d12 f_d2 f_d22 g g_d1 g_d11 g_d111 g_d112 g_d12 g_d122 g_d2 g_d22 t y0 a0 b bu th thu = 1 := by
  refine ⟨?_, ?_, ?_, ?_⟩ <;> simp only [Gen.adj_f_i_general_11_en_rg_out, Gen.adj_f_i_general_11_en_leaf_out, Gen.adj_f_i_general_11_en_rg_z_after, Gen.adj_f_i_general_11_en_leaf_z_after]

theorem adj_gp_i_general_11_ng_spec (f : K → K → K → K) (f_d1 : K → K → K → K) (f_d2 : K → K → K → K) (g : K → K → K → K) (g_d1 : K → K → K → K) (g_d11 : K → K → K → K) (g_d12 : K → K → K → K) (g_d2 : K → K → K → K) (t y0 a0 b bu th thu v0 : K) :
    Gen.adj_gp_i_general_11_ng_out_0_0 g g_d1 g_d2 t y0 a0 b bu th thu v0
      = gProdY (jet_general_11 f f_d1 f_d2 g g_d1 g_d11 g_d12 g_d2 t y0 th) ![v0] 0 ∧
    Gen.adj_gp_i_general_11_ng_out_0_1 g g_d1 g_d2 t y0 a0 b bu th thu v0
      = gProdA (jet_general_11 f f_d1 f_d2 g g_d1 g_d11 g_d12 g_d2 t y0 th) ![a0] ![v0] 0 ∧
    Gen.adj_gp_i_general_11_ng_out_0_2 g g_d1 g_d2 t y0 a0 b bu th thu v0
      = gProdTh (jet_general_11 f f_d1 f_d2 g g_d1 g_d11 g_d12 g_d2 t y0 th) ![a0] ![v0] 0 ∧
    Gen.adj_gp_i_general_11_ng_out_0_3 g g_d1 g_d2 t y0 a0 b bu th thu v0
      = gProdTh (jet_general_11 f f_d1 f_d2 g g_d1 g_d11 g_d12 g_d2 t y0 th) ![a0] ![v0] 1 := by
  refine ⟨?_, ?_, ?_, ?_⟩ <;>
  simp [Gen.adj_gp_i_general_11_ng_out_0_0, Gen.adj_gp_i_general_11_ng_out_0_1, Gen.adj_gp_i_general_11_ng_out_0_2, Gen.adj_gp_i_general_11_ng_out_0_3, jet_general_11, stratDriftY, stratDriftA, stratDriftTh, itoDriftY, itoDriftA, itoDriftTh, gProdY, gProdA, gProdTh, gdgY, gdgA, gdgTh, driftY, driftA, driftTh, diffY, diffA, diffTh, itoCorr, itoCorrY, itoCorrTh, fStrat, fStratY, fStratTh, colCorrY, colCorrA, colCorrTh, Fin.sum_univ_two, Fin.sum_univ_one, Fin.isValue, Matrix.cons_val_zero, Matrix.cons_val_one, Matrix.cons_val_fin_one, Matrix.head_cons] <;> ring

theorem adj_gp_i_general_11_ng_unused_param_zero (f : K → K → K → K) (f_d1 : K → K → K → K) (f_d2 : K → K → K → K) (g : K → K → K → K) (g_d1 : K → K → K → K) (g_d11 : K → K → K → K) (g_d12 : K → K → K → K) (g_d2 : K → K → K → K) (t y0 a0 b bu th thu v0 : K) :
    Gen.adj_gp_i_general_11_ng_out_0_3 g g_d1 g_d2 t y0 a0 b bu th thu v0 = 0 := by
  simp [Gen.adj_gp_i_general_11_ng_out_0_3]

theorem adj_gp_i_general_11_ng_graph (f : K → K → K → K) (f_d1 : K → K → K → K) (f_d2 : K → K → K → K) (g : K → K → K → K) (g_d1 : K → K → K → K) (g_d11 : K → K → K → K) (g_d12 : K → K → K → K) (g_d2 : K → K → K → K) (t y0 a0 b bu th thu v0 : K) :
    Gen.adj_gp_i_general_11_ng_rg_out g g_d1 g_d2 t y0 a0 b bu th thu v0 = 0 ∧
    Gen.adj_gp_i_general_11_ng_leaf_out g g_d1 g_d2 t y0 a0 b bu th thu v0 = 1 ∧
    Gen.adj_gp_i_general_11_ng_rg_z_after g g_d1 g_d2 t y0 a0 b bu th thu v0 = 0 ∧
    Gen.adj_gp_i_general_11_ng_leaf_z_after g g_d1 g_d2 t y0 a0 b bu th thu v0 = 1 := by
  refine ⟨?_, ?_, ?_, ?_⟩ <;> simp only [Gen.adj_gp_i_general_11_ng_rg_out, Gen.adj_gp_i_general_11_ng_leaf_out, Gen.adj_gp_i_general_11_ng_rg_z_after, Gen.adj_gp_i_general_11_ng_leaf_z_after]

theorem adj_gp_i_general_11_en_spec (f : K → K → K → K) (f_d1 : K → K → K → K) (f_d2 : K → K → K → K) (g : K → K → K → K) (g_d1 : K → K → K → K) (g_d11 : K → K → K → K) (g_d12 : K → K → K → K) (g_d2 : K → K → K → K) (g_d22 : K → K → K → K) (t y0 a0 b bu th thu v0 : K) :
    Gen.adj_gp_i_general_11_en_out_0_0 g g_d1 g_d11 g_d12 g_d2 g_d22 t y0 a0 b bu th thu v0
      = gProdY (jet_general_11 f f_d1 f_d2 g g_d1 g_d11 g_d12 g_d2 t y0 th) ![v0] 0 ∧
    Gen.adj_gp_i_general_11_en_out_0_1 g g_d1 g_d11 g_d12 g_d2 g_d22 t y0 a0 b bu th thu v0
      = gProdA (jet_general_11 f f_d1 f_d2 g g_d1 g_d11 g_d12 g_d2 t y0 th) ![a0] ![v0] 0 ∧
    Gen.adj_gp_i_general_11_en_out_0_2 g g_d1 g_d11 g_d12 g_d2 g_d22 t y0 a0 b bu th thu v0
      = gProdTh (jet_general_11 f f_d1 f_d2 g g_d1 g_d11 g_d12 g_d2 t y0 th) ![a0] ![v0] 0 ∧
    Gen.adj_gp_i_general_11_en_out_0_3 g g_d1 g_d11 g_d12 g_d2 g_d22 t y0 a0 b bu th thu v0
      = gProdTh (jet_general_11 f f_d1 f_d2 g g_d1 g_d11 g_d12 g_d2 t y0 th) ![a0] ![v0] 1 := by
  refine ⟨?_, ?_, ?_, ?_⟩ <;>
  simp [Gen.adj_gp_i_general_11_en_out_0_0, Gen.adj_gp_i_general_11_en_out_0_1, Gen.adj_gp_i_general_11_en_out_0_2, Gen.adj_gp_i_general_11_en_out_0_3, jet_general_11, stratDriftY, stratDriftA, stratDriftTh, itoDriftY, itoDriftA, itoDriftTh, gProdY, gProdA, gProdTh, gdgY, gdgA, gdgTh, driftY, driftA, driftTh, diffY, diffA, diffTh, itoCorr, itoCorrY, itoCorrTh, fStrat, fStratY, fStratTh, colCorrY, colCorrA, colCorrTh, Fin.sum_univ_two, Fin.sum_univ_one, Fin.isValue, Matrix.cons_val_zero, Matrix.cons_val_one, Matrix.cons_val_fin_one, Matrix.head_cons] <;> ring

theorem adj_gp_i_general_11_en_unused_param_zero (f : K → K → K → K) (f_d1 : K → K → K → K) (f_d2 : K → K → K → K) (g : K → K → K → K) (g_d1 : K → K → K → K) (g_d11 : K → K → K → K) (g_d12 : K → K → K → K) (g_d2 : K → K → K → K) (g_d22 : K → K → K → K) (t y0 a0 b bu th thu v0 : K) :
    Gen.adj_gp_i_general_11_en_out_0_3 g g_d1 g_d11 g_d12 g_d2 g_d22 t y0 a0 b bu th thu v0 = 0 := by
  simp [Gen.adj_gp_i_general_11_en_out_0_3]

theorem adj_gp_i_general_11_en_graph (f : K → K → K → K) (f_d1 : K → K → K → K) (f_d2 : K → K → K → K) (g : K → K → K → K) (g_d1 : K → K → K → K) (g_d11 : K → K → K → K) (g_d12 : K → K → K → K) (g_d2 : K → K → K → K) (g_d22 : K → K → K → K) (t y0 a0 b bu th thu v0 : K) :
    Gen.adj_gp_i_general_11_en_rg_out g g_d1 g_d11 g_d12 g_d2 g_d22 t y0 a0 b bu th thu v0 = 1 ∧
    Gen.adj_gp_i_general_11_en_leaf_out g g_d1 g_d11 g_d12 g_d2 g_d22 t y0 a0 b bu th thu v0 = 0 ∧
    Gen.adj_gp_i_general_11_en_rg_z_after g g_d1 g_d11 g_d12 g_d2 g_d22 t y0 a0 b bu th thu v0 = 1 ∧
    Gen.adj_gp_i_general_11_en_leaf_z_after g g_d1 g_d11 g_d12 g_d2 g_d22 t y0 a0 b bu th thu v0 = 1 := by
  refine ⟨?_, ?_, ?_, ?_⟩ <;> simp only [Gen.adj_gp_i_general_11_en_rg_out, Gen.adj_gp_i_general_11_en_leaf_out, Gen.adj_gp_i_general_11_en_rg_z_after, Gen.adj_gp_i_general_11_en_leaf_z_after]

theorem adj_fgp_i_general_11_ng_unused_param_zero (f : K → K → K → K) (f_d1 : K → K → K → K) (f_d2 : K → K → K → K) (g : K → K → K → K) (g_d1 : K → K → K → K) (g_d11 : K → K → K → K) (g_d12 : K → K → K → K) (g_d2 : K → K → K → K) (t y0 a0 b bu th thu v0 : K) :
    Gen.adj_fgp_i_general_11_ng_f_0_3 f f_d1 f_d2 g g_d1 g_d11 g_d12 g_d2 t y0 a0 b bu th thu v0 = 0 ∧
    Gen.adj_fgp_i_general_11_ng_gp_0_3 f f_d1 f_d2 g g_d1 g_d11 g_d12 g_d2 t y0 a0 b bu th thu v0 = 0 := by
  refine ⟨?_, ?_⟩ <;> simp [Gen.adj_fgp_i_general_11_ng_f_0_3, Gen.adj_fgp_i_general_11_ng_gp_0_3]

theorem adj_fgp_i_general_11_ng_pair (f : K → K → K → K) (f_d1 : K → K → K → K) (f_d2 : K → K → K → K) (g : K → K → K → K) (g_d1 : K → K → K → K) (g_d11 : K → K → K → K) (g_d12 : K → K → K → K) (g_d2 : K → K → K → K) (t y0 a0 b bu th thu v0 : K) :
    Gen.adj_fgp_i_general_11_ng_f_0_0 f f_d1 f_d2 g g_d1 g_d11 g_d12 g_d2 t y0 a0 b bu th thu v0
      = Gen.adj_f_i_general_11_ng_out_0_0 f f_d1 f_d2 g g_d1 g_d11 g_d12 g_d2 t y0 a0 b bu th thu ∧
    Gen.adj_fgp_i_general_11_ng_f_0_1 f f_d1 f_d2 g g_d1 g_d11 g_d12 g_d2 t y0 a0 b bu th thu v0
      = Gen.adj_f_i_general_11_ng_out_0_1 f f_d1 f_d2 g g_d1 g_d11 g_d12 g_d2 t y0 a0 b bu th thu ∧
    Gen.adj_fgp_i_general_11_ng_f_0_2 f f_d1 f_d2 g g_d1 g_d11 g_d12 g_d2 t y0 a0 b bu th thu v0
      = Gen.adj_f_i_general_11_ng_out_0_2 f f_d1 f_d2 g g_d1 g_d11 g_d12 g_d2 t y0 a0 b bu th thu ∧
    Gen.adj_fgp_i_general_11_ng_f_0_3 f f_d1 f_d2 g g_d1 g_d11 g_d12 g_d2 t y0 a0 b bu th thu v0
      = Gen.adj_f_i_general_11_ng_out_0_3 f f_d1 f_d2 g g_d1 g_d11 g_d12 g_d2 t y0 a0 b bu th thu ∧
    Gen.adj_fgp_i_general_11_ng_gp_0_0 f f_d1 f_d2 g g_d1 g_d11 g_d12 g_d2 t y0 a0 b bu th thu v0
      = Gen.adj_gp_i_general_11_ng_out_0_0 g g_d1 g_d2 t y0 a0 b bu th thu v0 ∧
    Gen.adj_fgp_i_general_11_ng_gp_0_1 f f_d1 f_d2 g g_d1 g_d11 g_d12 g_d2 t y0 a0 b bu th thu v0
      = Gen.adj_gp_i_general_11_ng_out_0_1 g g_d1 g_d2 t y0 a0 b bu th thu v0 ∧
    Gen.adj_fgp_i_general_11_ng_gp_0_2 f f_d1 f_d2 g g_d1 g_d11 g_d12 g_d2 t y0 a0 b bu th thu v0
      = Gen.adj_gp_i_general_11_ng_out_0_2 g g_d1 g_d2 t y0 a0 b bu th thu v0 ∧
    Gen.adj_fgp_i_general_11_ng_gp_0_3 f f_d1 f_d2 g g_d1 g_d11 g_d12 g_d2 t y0 a0 b bu th thu v0
      = Gen.adj_gp_i_general_11_ng_out_0_3 g g_d1 g_d2 t y0 a0 b bu th thu v0 := by
  refine ⟨?_, ?_, ?_, ?_, ?_, ?_, ?_, ?_⟩ <;> simp only [Gen.adj_fgp_i_general_11_ng_f_0_0, Gen.adj_f_i_general_11_ng_out_0_0, Gen.adj_fgp_i_general_11_ng_f_0_1, Gen.adj_f_i_general_11_ng_out_0_1, Gen.adj_fgp_i_general_11_ng_f_0_2, Gen.adj_f_i_general_11_ng_out_0_2, Gen.adj_fgp_i_general_11_ng_f_0_3, Gen.adj_f_i_general_11_ng_out_0_3, Gen.adj_fgp_i_general_11_ng_gp_0_0, Gen.adj_gp_i_general_11_ng_out_0_0, Gen.adj_fgp_i_general_11_ng_gp_0_1, Gen.adj_gp_i_general_11_ng_out_0_1, Gen.adj_fgp_i_general_11_ng_gp_0_2, Gen.adj_gp_i_general_11_ng_out_0_2, Gen.adj_fgp_i_general_11_ng_gp_0_3, Gen.adj_gp_i_general_11_ng_out_0_3] <;> ring

theorem adj_fgp_i_general_11_ng_graph (f : K → K → K → K) (f_d1 : K → K → K → K) (f_d2 : K → K → K → K) (g : K → K → K → K) (g_d1 : K → K → K → K) (g_d11 : K → K → K → K) (g_d12 : K → K → K → K) (g_d2 : K → K → K → K) (t y0 a0 b bu th thu v0 : K) :
    Gen.adj_fgp_i_general_11_ng_rg_f f f_d1 f_d2 g g_d1 g_d11 g_d12 g_d2 t y0 a0 b bu th thu v0 = 0 ∧
    Gen.adj_fgp_i_general_11_ng_leaf_f f f_d1 f_d2 g g_d1 g_d11 g_d12 g_d2 t y0 a0 b bu th thu v0 = 1 ∧
    Gen.adj_fgp_i_general_11_ng_rg_gp f f_d1 f_d2 g g_d1 g_d11 g_d12 g_d2 t y0 a0 b bu th thu v0 = 0 ∧
    Gen.adj_fgp_i_general_11_ng_leaf_gp f f_d1 f_d2 g g_d1 g_d11 g_d12 g_d2 t y0 a0 b bu th thu v0 = 1 ∧
    Gen.adj_fgp_i_general_11_ng_rg_z_after f f_d1 f_d2 g g_d1 g_d11 g_d12 g_d2 t y0 a0 b bu th thu v0 = 0 ∧
    Gen.adj_fgp_i_general_11_ng_leaf_z_after f f_d1 f_d2 g g_d1 g_d11 g_d12 g_d2 t y0 a0 b bu th thu v0 = 1 := by
  refine ⟨?_, ?_, ?_, ?_, ?_, ?_⟩ <;> simp only [Gen.adj_fgp_i_general_11_ng_rg_f, Gen.adj_fgp_i_general_11_ng_leaf_f, Gen.adj_fgp_i_general_11_ng_rg_gp, Gen.adj_fgp_i_general_11_ng_leaf_gp, Gen.adj_fgp_i_general_11_ng_rg_z_after, Gen.adj_fgp_i_general_11_ng_leaf_z_after]

theorem adj_fgp_i_general_11_en_unused_param_zero (f : K → K → K → K) (f_d1 : K → K → K → K) (f_d2 : K → K → K → K) (g : K → K → K → K) (g_d1 : K → K → K → K) (g_d11 : K → K → K → K) (g_d12 : K → K → K → K) (g_d2 : K → K → K → K) (t y0 a0 b bu th thu v0 : K) :
    Gen.adj_fgp_i_general_11_en_f_0_3 f f_d1 f_d2 g g_d1 g_d11 g_d12 g_d2 t y0 a0 b bu th thu v0 = 0 ∧
    Gen.adj_fgp_i_general_11_en_gp_0_3 f f_d1 f_d2 g g_d1 g_d11 g_d12 g_d2 t y0 a0 b bu th thu v0 = 0 := by
  refine ⟨?_, ?_⟩ <;> simp [Gen.adj_fgp_i_general_11_en_f_0_3, Gen.adj_fgp_i_general_11_en_gp_0_3]

theorem adj_fgp_i_general_11_en_pair (f : K → K → K → K) (f_d1 : K → K → K → K) (f_d2 : K → K → K → K) (g : K → K → K → K) (g_d1 : K → K → K → K) (g_d11 : K → K → K → K) (g_d12 : K → K → K → K) (g_d2 : K → K → K → K) (t y0 a0 b bu th thu v0 : K) :
    Gen.adj_fgp_i_general_11_en_f_0_0 f f_d1 f_d2 g g_d1 g_d11 g_d12 g_d2 t y0 a0 b bu th thu v0
      = Gen.adj_f_i_general_11_en_out_0_0 f f_d1 f_d11 f_d12 f_d2 f_d22 g g_d1 g_d11 g_d111 g_d112 g_d12 g_d122 g_d2 g_d22 t y0 a0 b bu th thu ∧
    Gen.adj_fgp_i_general_11_en_f_0_1 f f_d1 f_d2 g g_d1 g_d11 g_d12 g_d2 t y0 a0 b bu th thu v0
      = Gen.adj_f_i_general_11_en_out_0_1 f f_d1 f_d11 f_d12 f_d2 f_d22 g g_d1 g_d11 g_d111 g_d112 g_d12 g_d122 g_d2 g_d22 t y0 a0 b bu th thu ∧
    Gen.adj_fgp_i_general_11_en_f_0_2 f f_d1 f_d2 g g_d1 g_d11 g_d12 g_d2 t y0 a0 b bu th thu v0
      = Gen.adj_f_i_general_11_en_out_0_2 f f_d1 f_d11 f_d12 f_d2 f_d22 g g_d1 g_d11 g_d111 g_d112 g_d12 g_d122 g_d2 g_d22 t y0 a0 b bu th thu ∧
    Gen.adj_fgp_i_general_11_en_f_0_3 f f_d1 f_d2 g g_d1 g_d11 g_d12 g_d2 t y0 a0 b bu th thu v0
      = Gen.adj_f_i_general_11_en_out_0_3 f f_d1 f_d11 f_d12 f_d2 f_d22 g g_d1 g_d11 g_d111 g_d112 g_d12 g_d122 g_d2 g_d22 t y0 a0 b bu th thu ∧
    Gen.adj_fgp_i_general_11_en_gp_0_0 f f_d1 f_d2 g g_d1 g_d11 g_d12 g_d2 t y0 a0 b bu th thu v0
      = Gen.adj_gp_i_general_11_en_out_0_0 g g_d1 g_d11 g_d12 g_d2 g_d22 t y0 a0 b bu th thu v0 ∧
    Gen.adj_fgp_i_general_11_en_gp_0_1 f f_d1 f_d2 g g_d1 g_d11 g_d12 g_d2 t y0 a0 b bu th thu v0
      = Gen.adj_gp_i_general_11_en_out_0_1 g g_d1 g_d11 g_d12 g_d2 g_d22 t y0 a0 b bu th thu v0 ∧
    Gen.adj_fgp_i_general_11_en_gp_0_2 f f_d1 f_d2 g g_d1 g_d11 g_d12 g_d2 t y0 a0 b bu th thu v0
      = Gen.adj_gp_i_general_11_en_out_0_2 g g_d1 g_d11 g_d12 g_d2 g_d22 t y0 a0 b bu th thu v0 ∧
    Gen.adj_fgp_i_general_11_en_gp_0_3 f f_d1 f_d2 g g_d1 g_d11 g_d12 g_d2 t y0 a0 b bu th thu v0
      = Gen.adj_gp_i_general_11_en_out_0_3 g g_d1 g_d11 g_d12 g_d2 g_d22 t y0 a0 b bu th thu v0 := by
  refine ⟨?_, ?_, ?_, ?_, ?_, ?_, ?_, ?_⟩ <;> simp only [Gen.adj_fgp_i_general_11_en_f_0_0, Gen.adj_f_i_general_11_en_out_0_0, Gen.adj_fgp_i_general_11_en_f_0_1, Gen.adj_f_i_general_11_en_out_0_1, Gen.adj_fgp_i_general_11_en_f_0_2, Gen.adj_f_i_general_11_en_out_0_2, Gen.adj_fgp_i_general_11_en_f_0_3, Gen.adj_f_i_general_11_en_out_0_3, Gen.adj_fgp_i_general_11_en_gp_0_0, Gen.adj_gp_i_general_11_en_out_0_0, Gen.adj_fgp_i_general_11_en_gp_0_1, Gen.adj_gp_i_general_11_en_out_0_1, Gen.adj_fgp_i_general_11_en_gp_0_2, Gen.adj_gp_i_general_11_en_out_0_2, Gen.adj_fgp_i_general_11_en_gp_0_3, Gen.adj_gp_i_general_11_en_out_0_3] <;> ring

theorem adj_fgp_i_general_11_en_graph (f : K → K → K → K) (f_d1 : K → K → K → K) (f_d2 : K → K → K → K) (g : K → K → K → K) (g_d1 : K → K → K → K) (g_d11 : K → K → K → K) (g_d12 : K → K → K → K) (g_d2 : K → K → K → K) (t y0 a0 b bu th thu v0 : K) :
    Gen.adj_fgp_i_general_11_en_rg_f f f_d1 f_d2 g g_d1 g_d11 g_d12 g_d2 t y0 a0 b bu th thu v0 = 1 ∧
    Gen.adj_fgp_i_general_11_en_leaf_f f f_d1 f_d2 g g_d1 g_d11 g_d12 g_d2 t y0 a0 b bu th thu v0 = 0 ∧
    Gen.adj_fgp_i_general_11_en_rg_gp f f_d1 f_d2 g g_d1 g_d11 g_d12 g_d2 t y0 a0 b bu th thu v0 = 1 ∧
    Gen.adj_fgp_i_general_11_en_leaf_gp f f_d1 f_d2 g g_d1 g_d11 g_d12 g_d2 t y0 a0 b bu th thu v0 = 0 ∧
    Gen.adj_fgp_i_general_11_en_rg_z_after f f_d1 f_d2 g g_d1 g_d11 g_d12 g_d2 t y0 a0 b bu th thu v0 = 1 ∧
    Gen.adj_fgp_i_general_11_en_leaf_z_after f f_d1 f_d2 g g_d1 g_d11 g_d12 g_d2 t y0 a0 b bu th thu v0 = 1 := by
  refine ⟨?_, ?_, ?_, ?_, ?_, ?_⟩ <;> simp only [Gen.adj_fgp_i_general_11_en_rg_f, Gen.adj_fgp_i_general_11_en_leaf_f, Gen.adj_fgp_i_general_11_en_rg_gp, Gen.adj_fgp_i_general_11_en_leaf_gp, Gen.adj_fgp_i_general_11_en_rg_z_after, Gen.adj_fgp_i_general_11_en_leaf_z_after]

theorem adj_f_i_general_22_ng_spec (f0 : K → K → K → K → K) (f0_d1 : K → K → K → K → K) (f0_d2 : K → K → K → K → K) (f0_d3 : K → K → K → K → K) (f1 : K → K → K → K → K) (f1_d1 : K → K → K → K → K) (f1_d2 : K → K → K → K → K) (f1_d3 : K → K → K → K → K) (g00 : K → K → K → K → K) (g00_d1 : K → K → K → K → K) (g00_d11 : K → K → K → K → K) (g00_d12 : K → K → K → K → K) (g00_d13 : K → K → K → K → K) (g00_d2 : K → K → K → K → K) (g00_d22 : K → K → K → K → K) (g00_d23 : K → K → K → K → K) (g00_d3 : K → K → K → K → K) (g01 : K → K → K → K → K) (g01_d1 : K → K → K → K → K) (g01_d11 : K → K → K → K → K) (g01_d12 : K → K → K → K → K) (g01_d13 : K → K → K → K → K) (g01_d2 : K → K → K → K → K) (g01_d22 : K → K → K → K → K) (g01_d23 : K → K → K → K → K) (g01_d3 : K → K → K → K → K) (g10 : K → K → K → K → K) (g10_d1 : K → K → K → K → K) (g10_d11 : K → K → K → K → K) (g10_d12 : K → K → K → K → K) (g10_d13 : K → K → K → K → K) (g10_d2 : K → K → K → K → K) (g10_d22 : K → K → K → K → K) (g10_d23 : K → K → K → K → K) (g10_d3 : K → K → K → K → K) (g11 : K → K → K → K → K) (g11_d1 : K → K → K → K → K) (g11_d11 : K → K → K → K → K) (g11_d12 : K → K → K → K → K) (g11_d13 : K → K → K → K → K) (g11_d2 : K → K → K → K → K) (g11_d22 : K → K → K → K → K) (g11_d23 : K → K → K → K → K) (g11_d3 : K → K → K → K → K) (t y0 y1 a0 a1 b bu th thu : K) :
    Gen.adj_f_i_general_22_ng_out_0_0 f0 f0_d1 f0_d2 f0_d3 f1 f1_d1 f1_d2 f1_d3 g00 g00_d1 g00_d11 g00_d12 g00_d13 g00_d2 g00_d22 g00_d23 g00_d3 g01 g01_d1 g01_d11 g01_d12 g01_d13 g01_d2 g01_d22 g01_d23 g01_d3 g10 g10_d1 g10_d11 g10_d12 g10_d13 g10_d2 g10_d22 g10_d23 g10_d3 g11 g11_d1 g11_d11 g11_d12 g11_d13 g11_d2 g11_d22 g11_d23 g11_d3 t y0 y1 a0 a1 b bu th thu
      = itoDriftY (jet_general_22 f0 f0_d1 f0_d2 f0_d3 f1 f1_d1 f1_d2 f1_d3 g00 g00_d1 g00_d11 g00_d12 g00_d13 g00_d2 g00_d22 g00_d23 g00_d3 g01 g01_d1 g01_d11 g01_d12 g01_d13 g01_d2 g01_d22 g01_d23 g01_d3 g10 g10_d1 g10_d11 g10_d12 g10_d13 g10_d2 g10_d22 g10_d23 g10_d3 g11 g11_d1 g11_d11 g11_d12 g11_d13 g11_d2 g11_d22 g11_d23 g11_d3 t y0 y1 th) 0 ∧
    Gen.adj_f_i_general_22_ng_out_0_1 f0 f0_d1 f0_d2 f0_d3 f1 f1_d1 f1_d2 f1_d3 g00 g00_d1 g00_d11 g00_d12 g00_d13 g00_d2 g00_d22 g00_d23 g00_d3 g01 g01_d1 g01_d11 g01_d12 g01_d13 g01_d2 g01_d22 g01_d23 g01_d3 g10 g10_d1 g10_d11 g10_d12 g10_d13 g10_d2 g10_d22 g10_d23 g10_d3 g11 g11_d1 g11_d11 g11_d12 g11_d13 g11_d2 g11_d22 g11_d23 g11_d3 t y0 y1 a0 a1 b bu th thu
      = itoDriftY (jet_general_22 f0 f0_d1 f0_d2 f0_d3 f1 f1_d1 f1_d2 f1_d3 g00 g00_d1 g00_d11 g00_d12 g00_d13 g00_d2 g00_d22 g00_d23 g00_d3 g01 g01_d1 g01_d11 g01_d12 g01_d13 g01_d2 g01_d22 g01_d23 g01_d3 g10 g10_d1 g10_d11 g10_d12 g10_d13 g10_d2 g10_d22 g10_d23 g10_d3 g11 g11_d1 g11_d11 g11_d12 g11_d13 g11_d2 g11_d22 g11_d23 g11_d3 t y0 y1 th) 1 ∧
    Gen.adj_f_i_general_22_ng_out_0_2 f0 f0_d1 f0_d2 f0_d3 f1 f1_d1 f1_d2 f1_d3 g00 g00_d1 g00_d11 g00_d12 g00_d13 g00_d2 g00_d22 g00_d23 g00_d3 g01 g01_d1 g01_d11 g01_d12 g01_d13 g01_d2 g01_d22 g01_d23 g01_d3 g10 g10_d1 g10_d11 g10_d12 g10_d13 g10_d2 g10_d22 g10_d23 g10_d3 g11 g11_d1 g11_d11 g11_d12 g11_d13 g11_d2 g11_d22 g11_d23 g11_d3 t y0 y1 a0 a1 b bu th thu
      = itoDriftA (jet_general_22 f0 f0_d1 f0_d2 f0_d3 f1 f1_d1 f1_d2 f1_d3 g00 g00_d1 g00_d11 g00_d12 g00_d13 g00_d2 g00_d22 g00_d23 g00_d3 g01 g01_d1 g01_d11 g01_d12 g01_d13 g01_d2 g01_d22 g01_d23 g01_d3 g10 g10_d1 g10_d11 g10_d12 g10_d13 g10_d2 g10_d22 g10_d23 g10_d3 g11 g11_d1 g11_d11 g11_d12 g11_d13 g11_d2 g11_d22 g11_d23 g11_d3 t y0 y1 th) ![a0, a1] 0 ∧
    Gen.adj_f_i_general_22_ng_out_0_3 f0 f0_d1 f0_d2 f0_d3 f1 f1_d1 f1_d2 f1_d3 g00 g00_d1 g00_d11 g00_d12 g00_d13 g00_d2 g00_d22 g00_d23 g00_d3 g01 g01_d1 g01_d11 g01_d12 g01_d13 g01_d2 g01_d22 g01_d23 g01_d3 g10 g10_d1 g10_d11 g10_d12 g10_d13 g10_d2 g10_d22 g10_d23 g10_d3 g11 g11_d1 g11_d11 g11_d12 g11_d13 g11_d2 g11_d22 g11_d23 g11_d3 t y0 y1 a0 a1 b bu th thu
      = itoDriftA (jet_general_22 f0 f0_d1 f0_d2 f0_d3 f1 f1_d1 f1_d2 f1_d3 g00 g00_d1 g00_d11 g00_d12 g00_d13 g00_d2 g00_d22 g00_d23 g00_d3 g01 g01_d1 g01_d11 g01_d12 g01_d13 g01_d2 g01_d22 g01_d23 g01_d3 g10 g10_d1 g10_d11 g10_d12 g10_d13 g10_d2 g10_d22 g10_d23 g10_d3 g11 g11_d1 g11_d11 g11_d12 g11_d13 g11_d2 g11_d22 g11_d23 g11_d3 t y0 y1 th) ![a0, a1] 1 ∧
    Gen.adj_f_i_general_22_ng_out_0_4 f0 f0_d1 f0_d2 f0_d3 f1 f1_d1 f1_d2 f1_d3 g00 g00_d1 g00_d11 g00_d12 g00_d13 g00_d2 g00_d22 g00_d23 g00_d3 g01 g01_d1 g01_d11 g01_d12 g01_d13 g01_d2 g01_d22 g01_d23 g01_d3 g10 g10_d1 g10_d11 g10_d12 g10_d13 g10_d2 g10_d22 g10_d23 g10_d3 g11 g11_d1 g11_d11 g11_d12 g11_d13 g11_d2 g11_d22 g11_d23 g11_d3 t y0 y1 a0 a1 b bu th thu
      = itoDriftTh (jet_general_22 f0 f0_d1 f0_d2 f0_d3 f1 f1_d1 f1_d2 f1_d3 g00 g00_d1 g00_d11 g00_d12 g00_d13 g00_d2 g00_d22 g00_d23 g00_d3 g01 g01_d1 g01_d11 g01_d12 g01_d13 g01_d2 g01_d22 g01_d23 g01_d3 g10 g10_d1 g10_d11 g10_d12 g10_d13 g10_d2 g10_d22 g10_d23 g10_d3 g11 g11_d1 g11_d11 g11_d12 g11_d13 g11_d2 g11_d22 g11_d23 g11_d3 t y0 y1 th) ![a0, a1] 0 ∧
    Gen.adj_f_i_general_22_ng_out_0_5 f0 f0_d1 f0_d2 f0_d3 f1 f1_d1 f1_d2 f1_d3 g00 g00_d1 g00_d11 g00_d12 g00_d13 g00_d2 g00_d22 g00_d23 g00_d3 g01 g01_d1 g01_d11 g01_d12 g01_d13 g01_d2 g01_d22 g01_d23 g01_d3 g10 g10_d1 g10_d11 g10_d12 g10_d13 g10_d2 g10_d22 g10_d23 g10_d3 g11 g11_d1 g11_d11 g11_d12 g11_d13 g11_d2 g11_d22 g11_d23 g11_d3 t y0 y1 a0 a1 b bu th thu
      = itoDriftTh (jet_general_22 f0 f0_d1 f0_d2 f0_d3 f1 f1_d1 f1_d2 f1_d3 g00 g00_d1 g00_d11 g00_d12 g00_d13 g00_d2 g00_d22 g00_d23 g00_d3 g01 g01_d1 g01_d11 g01_d12 g01_d13 g01_d2 g01_d22 g01_d23 g01_d3 g10 g10_d1 g10_d11 g10_d12 g10_d13 g10_d2 g10_d22 g10_d23 g10_d3 g11 g11_d1 g11_d11 g11_d12 g11_d13 g11_d2 g11_d22 g11_d23 g11_d3 t y0 y1 th) ![a0, a1] 1 := by
  refine ⟨?_, ?_, ?_, ?_, ?_, ?_⟩ <;>
  simp [Gen.adj_f_i_general_22_ng_out_0_0, Gen.adj_f_i_general_22_ng_out_0_1, Gen.adj_f_i_general_22_ng_out_0_2, Gen.adj_f_i_general_22_ng_out_0_3, Gen.adj_f_i_general_22_ng_out_0_4, Gen.adj_f_i_general_22_ng_out_0_5, jet_general_22, stratDriftY, stratDriftA, stratDriftTh, itoDriftY, itoDriftA, itoDriftTh, gProdY, gProdA, gProdTh, gdgY, gdgA, gdgTh, driftY, driftA, driftTh, diffY, diffA, diffTh, itoCorr, itoCorrY, itoCorrTh, fStrat, fStratY, fStratTh, colCorrY, colCorrA, colCorrTh, Fin.sum_univ_two, Fin.sum_univ_one, Fin.isValue, Matrix.cons_val_zero, Matrix.cons_val_one, Matrix.cons_val_fin_one, Matrix.head_cons] <;> ring

theorem adj_f_i_general_22_ng_unused_param_zero (f0 : K → K → K → K → K) (f0_d1 : K → K → K → K → K) (f0_d2 : K → K → K → K → K) (f0_d3 : K → K → K → K → K) (f1 : K → K → K → K → K) (f1_d1 : K → K → K → K → K) (f1_d2 : K → K → K → K → K) (f1_d3 : K → K → K → K → K) (g00 : K → K → K → K → K) (g00_d1 : K → K → K → K → K) (g00_d11 : K → K → K → K → K) (g00_d12 : K → K → K → K → K) (g00_d13 : K → K → K → K → K) (g00_d2 : K → K → K → K → K) (g00_d22 : K → K → K → K → K) (g00_d23 : K → K → K → K → K) (g00_d3 : K → K → K → K → K) (g01 : K → K → K → K → K) (g01_d1 : K → K → K → K → K) (g01_d11 : K → K → K → K → K) (g01_d12 : K → K → K → K → K) (g01_d13 : K → K → K → K → K) (g01_d2 : K → K → K → K → K) (g01_d22 : K → K → K → K → K) (g01_d23 : K → K → K → K → K) (g01_d3 : K → K → K → K → K) (g10 : K → K → K → K → K) (g10_d1 : K → K → K → K → K) (g10_d11 : K → K → K → K → K) (g10_d12 : K → K → K → K → K) (g10_d13 : K → K → K → K → K) (g10_d2 : K → K → K → K → K) (g10_d22 : K → K → K → K → K) (g10_d23 : K → K → K → K → K) (g10_d3 : K → K → K → K → K) (g11 : K → K → K → K → K) (g11_d1 : K → K → K → K → K) (g11_d11 : K → K → K → K → K) (g11_d12 : K → K → K → K → K) (g11_d13 : K → K → K → K → K) (g11_d2 : K → K → K → K → K) (g11_d22 : K → K → K → K → K) (g11_d23 : K → K → K → K → K) (g11_d3 : K → K → K → K → K) (t y0 y1 a0 a1 b bu th thu : K) :
    Gen.adj_f_i_general_22_ng_out_0_5 f0 f0_d1 f0_d2 f0_d3 f1 f1_d1 f1_d2 f1_d3 g00 g00_d1 g00_d11 g00_d12 g00_d13 g00_d2 g00_d22 g00_d23 g00_d3 g01 g01_d1 g01_d11 g01_d12 g01_d13 g01_d2 g01_d22 g01_d23 g01_d3 g10 g10_d1 g10_d11 g10_d12 g10_d13 g10_d2 g10_d22 g10_d23 g10_d3 g11 g11_d1 g11_d11 g11_d12 g11_d13 g11_d2 g11_d22 g11_d23 g11_d3 t y0 y1 a0 a1 b bu th thu = 0 := by
  simp [Gen.adj_f_i_general_22_ng_out_0_5]

theorem adj_f_i_general_22_ng_graph (f0 : K → K → K → K → K) (f0_d1 : K → K → K → K → K) (f0_d2 : K → K → K → K → K) (f0_d3 : K → K → K → K → K) (f1 : K → K → K → K → K) (f1_d1 : K → K → K → K → K) (f1_d2 : K → K → K → K → K) (f1_d3 : K → K → K → K → K) (g00 : K → K → K → K → K) (g00_d1 : K → K → K → K → K) (g00_d11 : K → K → K → K → K) (g00_d12 : K → K → K → K → K) (g00_d13 : K → K → K → K → K) (g00_d2 : K → K → K → K → K) (g00_d22 : K → K → K → K → K) (g00_d23 : K → K → K → K → K) (g00_d3 : K → K → K → K → K) (g01 : K → K → K → K → K) (g01_d1 : K → K → K → K → K) (g01_d11 : K → K → K → K → K) (g01_d12 : K → K → K → K → K) (g01_d13 : K → K → K → K → K) (g01_d2 : K → K → K → K → K) (g01_d22 : K → K → K → K → K) (g01_d23 : K → K → K → K → K) (g01_d3 : K → K → K → K → K) (g10 : K → K → K → K → K) (g10_d1 : K → K → K → K → K) (g10_d11 : K → K → K → K → K) (g10_d12 : K → K → K → K → K) (g10_d13 : K → K → K → K → K) (g10_d2 : K → K → K → K → K) (g10_d22 : K → K → K → K → K) (g10_d23 : K → K → K → K → K) (g10_d3 : K → K → K → K → K) (g11 : K → K → K → K → K) (g11_d1 : K → K → K → K → K) (g11_d11 : K → K → K → K → K) (g11_d12 : K → K → K → K → K) (g11_d13 : K → K → K → K → K) (g11_d2 : K → K → K → K → K) (g11_d22 : K → K → K → K → K) (g11_d23 : K → K → K → K → K) (g11_d3 : K → K → K → K → K) (t y0 y1 a0 a1 b bu th thu : K) :
    Gen.adj_f_i_general_22_ng_rg_out f0 f0_d1 f0_d2 f0_d3 f1 f1_d1 f1_d2 f1_d3 g00 g00_d1 g00_d11 g00_d12 g00_d13 g00_d2 g00_d22 g00_d23 g00_d3 g01 g01_d1 g01_d11 g01_d12 g01_d13 g01_d2 g01_d22 g01_d23 g01_d3 g10 g10_d1 g10_d11 g10_d12 g10_d13 g10_d2 g10_d22 g10_d23 g10_d3 g11 g11_d1 g11_d11 g11_d12 g11_d13 g11_d2 g11_d22 g11_d23 g11_d3 t y0 y1 a0 a1 b bu th thu = 0 ∧
    Gen.adj_f_i_general_22_ng_leaf_out f0 f0_d1 f0_d2 f0_d3 f1 f1_d1 f1_d2 f1_d3 g00 g00_d1 g00_d11 g00_d12 g00_d13 g00_d2 g00_d22 g00_d23 g00_d3 g01 g01_d1 g01_d11 g01_d12 g01_d13 g01_d2 g01_d22 g01_d23 g01_d3 g10 g10_d1 g10_d11 g10_d12 g10_d13 g10_d2 g10_d22 g10_d23 g10_d3 g11 g11_d1 g11_d11 g11_d12 g11_d13 g11_d2 g11_d22 g11_d23 g11_d3 t y0 y1 a0 a1 b bu th thu = 1 ∧
    Gen.adj_f_i_general_22_ng_rg_z_after f0 f0_d1 f0_d2 f0_d3 f1 f1_d1 f1_d2 f1_d3 g00 g00_d1 g00_d11 g00_d12 g00_d13 g00_d2 g00_d22 g00_d23 g00_d3 g01 g01_d1 g01_d11 g01_d12 g01_d13 g01_d2 g01_d22 g01_d23 g01_d3 g10 g10_d1 g10_d11 g10_d12 g10_d13 g10_d2 g10_d22 g10_d23 g10_d3 g11 g11_d1 g11_d11 g11_d12 g11_d13 g11_d2 g11_d22 g11_d23 g11_d3 t y0 y1 a0 a1 b bu th thu = 0 ∧
    Gen.adj_f_i_general_22_ng_leaf_z_after f0 f0_d1 f0_d2 f0_d3 f1 f1_d1 f1_d2 f1_d3 g00 g00_d1 g00_d11 g00_d12 g00_d13 g00_d2 g00_d22 g00_d23 g00_d3 g01 g01_d1 g01_d11 g01_d12 g01_d13 g01_d2 g01_d22 g01_d23 g01_d3 g10 g10_d1 g10_d11 g10_d12 g10_d13 g10_d2 g10_d22 g10_d23 g10_d3 g11 g11_d1 g11_d11 g11_d12 g11_d13 g11_d2 g11_d22 g11_d23 g11_d3 t y0 y1 a0 a1 b bu th thu = 1 := by
  refine ⟨?_, ?_, ?_, ?_⟩ <;> simp only [Gen.adj_f_i_general_22_ng_rg_out, Gen.adj_f_i_general_22_ng_leaf_out, Gen.adj_f_i_general_22_ng_rg_z_after, Gen.adj_f_i_general_22_ng_leaf_z_after]

theorem adj_f_i_general_22_en_spec (f0 : K → K → K → K → K) (f0_d1 : K → K → K → K → K) (f0_d2 : K → K → K → K → K) (f0_d3 : K → K → K → K → K) (f1 : K → K → K → K → K) (f1_d1 : K → K → K → K → K) (f1_d2 : K → K → K → K → K) (f1_d3 : K → K → K → K → K) (g00 : K → K → K → K → K) (g00_d1 : K → K → K → K → K) (g00_d11 : K → K → K → K → K) (g00_d12 : K → K → K → K → K) (g00_d13 : K → K → K → K → K) (g00_d2 : K → K → K → K → K) (g00_d22 : K → K → K → K → K) (g00_d23 : K → K → K → K → K) (g00_d3 : K → K → K → K → K) (g01 : K → K → K → K → K) (g01_d1 : K → K → K → K → K) (g01_d11 : K → K → K → K → K) (g01_d12 : K → K → K → K → K) (g01_d13 : K → K → K → K → K) (g01_d2 : K → K → K → K → K) (g01_d22 : K → K → K → K → K) (g01_d23 : K → K → K → K → K) (g01_d3 : K → K → K → K → K) (g10 : K → K → K → K → K) (g10_d1 : K → K → K → K → K) (g10_d11 : K → K → K → K → K) (g10_d12 : K → K → K → K → K) (g10_d13 : K → K → K → K → K) (g10_d2 : K → K → K → K → K) (g10_d22 : K → K → K → K → K) (g10_d23 : K → K → K → K → K) (g10_d3 : K → K → K → K → K) (g11 : K → K → K → K → K) (g11_d1 : K → K → K → K → K) (g11_d11 : K → K → K → K → K) (g11_d12 : K → K → K → K → K) (g11_d13 : K → K → K → K → K) (g11_d2 : K → K → K → K → K) (g11_d22 : K → K → K → K → K) (g11_d23 : K → K → K → K → K) (g11_d3 : K → K → K → K → K) (t y0 y1 a0 a1 b bu th thu : K) :
    Gen.adj_f_i_general_22_en_out_0_0 f0 f0_d1 f0_d2 f0_d3 f1 f1_d1 f1_d2 f1_d3 g00 g00_d1 g00_d11 g00_d12 g00_d13 g00_d2 g00_d22 g00_d23 g00_d3 g01 g01_d1 g01_d11 g01_d12 g01_d13 g01_d2 g01_d22 g01_d23 g01_d3 g10 g10_d1 g10_d11 g10_d12 g10_d13 g10_d2 g10_d22 g10_d23 g10_d3 g11 g11_d1 g11_d11 g11_d12 g11_d13 g11_d2 g11_d22 g11_d23 g11_d3 t y0 y1 a0 a1 b bu th thu
      = itoDriftY (jet_general_22 f0 f0_d1 f0_d2 f0_d3 f1 f1_d1 f1_d2 f1_d3 g00 g00_d1 g00_d11 g00_d12 g00_d13 g00_d2 g00_d22 g00_d23 g00_d3 g01 g01_d1 g01_d11 g01_d12 g01_d13 g01_d2 g01_d22 g01_d23 g01_d3 g10 g10_d1 g10_d11 g10_d12 g10_d13 g10_d2 g10_d22 g10_d23 g10_d3 g11 g11_d1 g11_d11 g11_d12 g11_d13 g11_d2 g11_d22 g11_d23 g11_d3 t y0 y1 th) 0 ∧
    Gen.adj_f_i_general_22_en_out_0_1 f0 f0_d1 f0_d2 f0_d3 f1 f1_d1 f1_d2 f1_d3 g00 g00_d1 g00_d11 g00_d12 g00_d13 g00_d2 g00_d22 g00_d23 g00_d3 g01 g01_d1 g01_d11 g01_d12 g01_d13 g01_d2 g01_d22 g01_d23 g01_d3 g10 g10_d1 g10_d11 g10_d12 g10_d13 g10_d2 g10_d22 g10_d23 g10_d3 g11 g11_d1 g11_d11 g11_d12 g11_d13 g11_d2 g11_d22 g11_d23 g11_d3 t y0 y1 a0 a1 b bu th thu
      = itoDriftY (jet_general_22 f0 f0_d1 f0_d2 f0_d3 f1 f1_d1 f1_d2 f1_d3 g00 g00_d1 g00_d11 g00_d12 g00_d13 g00_d2 g00_d22 g00_d23 g00_d3 g01 g01_d1 g01_d11 g01_d12 g01_d13 g01_d2 g01_d22 g01_d23 g01_d3 g10 g10_d1 g10_d11 g10_d12 g10_d13 g10_d2 g10_d22 g10_d23 g10_d3 g11 g11_d1 g11_d11 g11_d12 g11_d13 g11_d2 g11_d22 g11_d23 g11_d3 t y0 y1 th) 1 ∧
    Gen.adj_f_i_general_22_en_out_0_2 f0 f0_d1 f0_d2 f0_d3 f1 f1_d1 f1_d2 f1_d3 g00 g00_d1 g00_d11 g00_d12 g00_d13 g00_d2 g00_d22 g00_d23 g00_d3 g01 g01_d1 g01_d11 g01_d12 g01_d13 g01_d2 g01_d22 g01_d23 g01_d3 g10 g10_d1 g10_d11 g10_d12 g10_d13 g10_d2 g10_d22 g10_d23 g10_d3 g11 g11_d1 g11_d11 g11_d12 g11_d13 g11_d2 g11_d22 g11_d23 g11_d3 t y0 y1 a0 a1 b bu th thu
      = itoDriftA (jet_general_22 f0 f0_d1 f0_d2 f0_d3 f1 f1_d1 f1_d2 f1_d3 g00 g00_d1 g00_d11 g00_d12 g00_d13 g00_d2 g00_d22 g00_d23 g00_d3 g01 g01_d1 g01_d11 g01_d12 g01_d13 g01_d2 g01_d22 g01_d23 g01_d3 g10 g10_d1 g10_d11 g10_d12 g10_d13 g10_d2 g10_d22 g10_d23 g10_d3 g11 g11_d1 g11_d11 g11_d12 g11_d13 g11_d2 g11_d22 g11_d23 g11_d3 t y0 y1 th) ![a0, a1] 0 ∧
    Gen.adj_f_i_general_22_en_out_0_3 f0 f0_d1 f0_d2 f0_d3 f1 f1_d1 f1_d2 f1_d3 g00 g00_d1 g00_d11 g00_d12 g00_d13 g00_d2 g00_d22 g00_d23 g00_d3 g01 g01_d1 g01_d11 g01_d12 g01_d13 g01_d2 g01_d22 g01_d23 g01_d3 g10 g10_d1 g10_d11 g10_d12 g10_d13 g10_d2 g10_d22 g10_d23 g10_d3 g11 g11_d1 g11_d11 g11_d12 g11_d13 g11_d2 g11_d22 g11_d23 g11_d3 t y0 y1 a0 a1 b bu th thu
      = itoDriftA (jet_general_22 f0 f0_d1 f0_d2 f0_d3 f1 f1_d1 f1_d2 f1_d3 g00 g00_d1 g00_d11 g00_d12 g00_d13 g00_d2 g00_d22 g00_d23 g00_d3 g01 g01_d1 g01_d11 g01_d12 g01_d13 g01_d2 g01_d22 g01_d23 g01_d3 g10 g10_d1 g10_d11 g10_d12 g10_d13 g10_d2 g10_d22 g10_d23 g10_d3 g11 g11_d1 g11_d11 g11_d12 g11_d13 g11_d2 g11_d22 g11_d23 g11_d3 t y0 y1 th) ![a0, a1] 1 ∧
    Gen.adj_f_i_general_22_en_out_0_4 f0 f0_d1 f0_d2 f0_d3 f1 f1_d1 f1_d2 f1_d3 g00 g00_d1 g00_d11 g00_d12 g00_d13 g00_d2 g00_d22 g00_d23 g00_d3 g01 g01_d1 g01_d11 g01_d12 g01_d13 g01_d2 g01_d22 g01_d23 g01_d3 g10 g10_d1 g10_d11 g10_d12 g10_d13 g10_d2 g10_d22 g10_d23 g10_d3 g11 g11_d1 g11_d11 g11_d12 g11_d13 g11_d2 g11_d22 g11_d23 g11_d3 t y0 y1 a0 a1 b bu th thu
      = itoDriftTh (jet_general_22 f0 f0_d1 f0_d2 f0_d3 f1 f1_d1 f1_d2 f1_d3 g00 g00_d1 g00_d11 g00_d12 g00_d13 g00_d2 g00_d22 g00_d23 g00_d3 g01 g01_d1 g01_d11 g01_d12 g01_d13 g01_d2 g01_d22 g01_d23 g01_d3 g10 g10_d1 g10_d11 g10_d12 g10_d13 g10_d2 g10_d22 g10_d23 g10_d3 g11 g11_d1 g11_d11 g11_d12 g11_d13 g11_d2 g11_d22 g11_d23 g11_d3 t y0 y1 th) ![a0, a1] 0 ∧
    Gen.adj_f_i_general_22_en_out_0_5 f0 f0_d1 f0_d2 f0_d3 f1 f1_d1 f1_d2 f1_d3 g00 g00_d1 g00_d11 g00_d12 g00_d13 g00_d2 g00_d22 g00_d23 g00_d3 g01 g01_d1 g01_d11 g01_d12 g01_d13 g01_d2 g01_d22 g01_d23 g01_d3 g10 g10_d1 g10_d11 g10_d12 g10_d13 g10_d2 g10_d22 g10_d23 g10_d3 g11 g11_d1 g11_d11 g11_d12 g11_d13 g11_d2 g11_d22 g11_d23 g11_d3 t y0 y1 a0 a1 b bu th thu
      = itoDriftTh (jet_general_22 f0 f0_d1 f0_d2 f0_d3 f1 f1_d1 f1_d2 f1_d3 g00 g00_d1 g00_d11 g00_d12 g00_d13 g00_d2 g00_d22 g00_d23 g00_d3 g01 g01_d1 g01_d11 g01_d12 g01_d13 g01_d2 g01_d22 g01_d23 g01_d3 g10 g10_d1 g10_d11 g10_d12 g10_d13 g10_d2 g10_d22 g10_d23 g10_d3 g11 g11_d1 g11_d11 g11_d12 g11_d13 g11_d2 g11_d22 g11_d23 g11_d3 t y0 y1 th) ![a0, a1] 1 := by
  refine ⟨?_, ?_, ?_, ?_, ?_, ?_⟩ <;>
  simp [Gen.adj_f_i_general_22_en_out_0_0, Gen.adj_f_i_general_22_en_out_0_1, Gen.adj_f_i_general_22_en_out_0_2, Gen.adj_f_i_general_22_en_out_0_3, Gen.adj_f_i_general_22_en_out_0_4, Gen.adj_f_i_general_22_en_out_0_5, jet_general_22, stratDriftY, stratDriftA, stratDriftTh, itoDriftY, itoDriftA, itoDriftTh, gProdY, gProdA, gProdTh, gdgY, gdgA, gdgTh, driftY, driftA, driftTh, diffY, diffA, diffTh, itoCorr, itoCorrY, itoCorrTh, fStrat, fStratY, fStratTh, colCorrY, colCorrA, colCorrTh, Fin.sum_univ_two, Fin.sum_univ_one, Fin.isValue, Matrix.cons_val_zero, Matrix.cons_val_one, Matrix.cons_val_fin_one, Matrix.head_cons] <;> ring

theorem adj_f_i_general_22_en_unused_param_zero (f0 : K → K → K → K → K) (f0_d1 : K → K → K → K → K) (f0_d2 : K → K → K → K → K) (f0_d3 : K → K → K → K → K) (f1 : K → K → K → K → K) (f1_d1 : K → K → K → K → K) (f1_d2 : K → K → K → K → K) (f1_d3 : K → K → K → K → K) (g00 : K → K → K → K → K) (g00_d1 : K → K → K → K → K) (g00_d11 : K → K → K → K → K) (g00_d12 : K → K → K → K → K) (g00_d13 : K → K → K → K → K) (g00_d2 : K → K → K → K → K) (g00_d22 : K → K → K → K → K) (g00_d23 : K → K → K → K → K) (g00_d3 : K → K → K → K → K) (g01 : K → K → K → K → K) (g01_d1 : K → K → K → K → K) (g01_d11 : K → K → K → K → K) (g01_d12 : K → K → K → K → K) (g01_d13 : K → K → K → K → K) (g01_d2 : K → K → K → K → K) (g01_d22 : K → K → K → K → K) (g01_d23 : K → K → K → K → K) (g01_d3 : K → K → K → K → K) (g10 : K → K → K → K → K) (g10_d1 : K → K → K → K → K) (g10_d11 : K → K → K → K → K) (g10_d12 : K → K → K → K → K) (g10_d13 : K → K → K → K → K) (g10_d2 : K → K → K → K → K) (g10_d22 : K → K → K → K → K) (g10_d23 : K → K → K → K → K) (g10_d3 : K → K → K → K → K) (g11 : K → K → K → K → K) (g11_d1 : K → K → K → K → K) (g11_d11 : K → K → K → K → K) (g11_d12 : K → K → K → K → K) (g11_d13 : K → K → K → K → K) (g11_d2 : K → K → K → K → K) (g11_d22 : K → K → K → K → K) (g11_d23 : K → K → K → K → K) (g11_d3 : K → K → K → K → K) (t y0 y1 a0 a1 b bu th thu : K) :
    Gen.adj_f_i_general_22_en_out_0_5 f0 f0_d1 f0_d2 f0_d3 f1 f1_d1 f1_d2 f1_d3 g00 g00_d1 g00_d11 g00_d12 g00_d13 g00_d2 g00_d22 g00_d23 g00_d3 g01 g01_d1 g01_d11 g01_d12 g01_d13 g01_d2 g01_d22 g01_d23 g01_d3 g10 g10_d1 g10_d11 g10_d12 g10_d13 g10_d2 g10_d22 g10_d23 g10_d3 g11 g11_d1 g11_d11 g11_d12 g11_d13 g11_d2 g11_d22 g11_d23 g11_d3 t y0 y1 a0 a1 b bu th thu = 0 := by
  simp [Gen.adj_f_i_general_22_en_out_0_5]

theorem adj_f_i_general_22_en_graph (f0 : K → K → K → K → K) (f0_d1 : K → K → K → K → K) (f0_d2 : K → K → K → K → K) (f0_d3 : K → K → K → K → K) (f1 : K → K → K → K → K) (f1_d1 : K → K → K → K → K) (f1_d2 : K → K → K → K → K) (f1_d3 : K → K → K → K → K) (g00 : K → K → K → K → K) (g00_d1 : K → K → K → K → K) (g00_d11 : K → K → K → K → K) (g00_d12 : K → K → K → K → K) (g00_d13 : K → K → K → K → K) (g00_d2 : K → K → K → K → K) (g00_d22 : K → K → K → K → K) (g00_d23 : K → K → K → K → K) (g00_d3 : K → K → K → K → K) (g01 : K → K → K → K → K) (g01_d1 : K → K → K → K → K) (g01_d11 : K → K → K → K → K) (g01_d12 : K → K → K → K → K) (g01_d13 : K → K → K → K → K) (g01_d2 : K → K → K → K → K) (g01_d22 : K → K → K → K → K) (g01_d23 : K → K → K → K → K) (g01_d3 : K → K → K → K → K) (g10 : K → K → K → K → K) (g10_d1 : K → K → K → K → K) (g10_d11 : K → K → K → K → K) (g10_d12 : K → K → K → K → K) (g10_d13 : K → K → K → K → K) (g10_d2 : K → K → K → K → K) (g10_d22 : K → K → K → K → K) (g10_d23 : K → K → K → K → K) (g10_d3 : K → K → K → K → K) (g11 : K → K → K → K → K) (g11_d1 : K → K → K → K → K) (g11_d11 : K → K → K → K → K) (g11_d12 : K → K → K → K → K) (g11_d13 : K → K → K → K → K) (g11_d2 : K → K → K → K → K) (g11_d22 : K → K → K → K → K) (g11_d23 : K → K → K → K → K) (g11_d3 : K → K → K → K → K) (t y0 y1 a0 a1 b bu th thu : K) :
    Gen.adj_f_i_general_22_en_rg_out f0 f0_d1 f0_d2 f0_d3 f1 f1_d1 f1_d2 f1_d3 g00 g00_d1 g00_d11 g00_d12 g00_d13 g00_d2 g00_d22 g00_d23 g00_d3 g01 g01_d1 g01_d11 g01_d12 g01_d13 g01_d2 g01_d22 g01_d23 g01_d3 g10 g10_d1 g10_d11 g10_d12 g10_d13 g10_d2 g10_d22 g10_d23 g10_d3 g11 g11_d1 g11_d11 g11_d12 g11_d13 g11_d2 g11_d22 g11_d23 g11_d3 t y0 y1 a0 a1 b bu th thu = 1 ∧
    Gen.adj_f_i_general_22_en_leaf_out f0 f0_d1 f0_d2 f0_d3 f1 f1_d1 f1_d2 f1_d3 g00 g00_d1 g00_d11 g00_d12 g00_d13 g00_d2 g00_d22 g00_d23 g00_d3 g01 g01_d1 g01_d11 g01_d12 g01_d13 g01_d2 g01_d22 g01_d23 g01_d3 g10 g10_d1 g10_d11 g10_d12 g10_d13 g10_d2 g10_d22 g10_d23 g10_d3 g11 g11_d1 g11_d11 g11_d12 g11_d13 g11_d2 g11_d22 g11_d23 g11_d3 t y0 y1 a0 a1 b bu th thu = 0 ∧
    Gen.adj_f_i_general_22_en_rg_z_after f0 f0_d1 f0_d2 f0_d3 f1 f1_d1 f1_d2 f1_d3 g00 g00_d1 g00_d11 g00_d12 g00_d13 g00_d2 g00_d22 g00_d23 g00_d3 g01 g01_d1 g01_d11 g01_d12 g01_d13 g01_d2 g01_d22 g01_d23 g01_d3 g10 g10_d1 g10_d11 g10_d12 g10_d13 g10_d2 g10_d22 g10_d23 g10_d3 g11 g11_d1 g11_d11 g11_d12 g11_d13 g11_d2 g11_d22 g11_d23 g11_d3 t y0 y1 a0 a1 b bu th thu = 1 ∧
    Gen.adj_f_i_general_22_en_leaf_z_after f0 f0_d1 f0_d2 f0_d3 f1 f1_d1 f1_d2 f1_d3 g00 g00_d1 g00_d11 g00_d12 g00_d13 g00_d2 g00_d22 g00_d23 g00_d3 g01 g01_d1 g01_d11 g01_d12 g01_d13 g01_d2 g01_d22 g01_d23 g01_d3 g10 g10_d1 g10_d11 g10_d12 g10_d13 g10_d2 g10_d22 g10_d23 g10_d3 g11 g11_d1 g11_d11 g11_d12 g11_d13 g11_d2 g11_d22 g11_d23 g11_d3 t y0 y1 a0 a1 b bu th thu = 1 := by
  refine ⟨?_, ?_, ?_, ?_⟩ <;> simp only [Gen.adj_f_i_general_22_en_rg_out, Gen.adj_f_i_general_22_en_leaf_out, Gen.adj_f_i_general_22_en_rg_z_after, Gen.adj_f_i_general_22_en_leaf_z_after]

theorem adj_gp_i_general_22_ng_spec (f0 : K → K → K → K → K) (f0_d1 : K → K → K → K → K) (f0_d2 : K → K → K → K → K) (f0_d3 : K → K → K → K → K) (f1 : K → K → K → K → K) (f1_d1 : K → K → K → K → K) (f1_d2 : K → K → K → K → K) (f1_d3 : K → K → K → K → K) (g00 : K → K → K → K → K) (g00_d1 : K → K → K → K → K) (g00_d11 : K → K → K → K → K) (g00_d12 : K → K → K → K → K) (g00_d13 : K → K → K → K → K) (g00_d2 : K → K → K → K → K) (g00_d22 : K → K → K → K → K) (g00_d23 : K → K → K → K → K) (g00_d3 : K → K → K → K → K) (g01 : K → K → K → K → K) (g01_d1 : K → K → K → K → K) (g01_d11 : K → K → K → K → K) (g01_d12 : K → K → K → K → K) (g01_d13 : K → K → K → K → K) (g01_d2 : K → K → K → K → K) (g01_d22 : K → K → K → K → K) (g01_d23 : K → K → K → K → K) (g01_d3 : K → K → K → K → K) (g10 : K → K → K → K → K) (g10_d1 : K → K → K → K → K) (g10_d11 : K → K → K → K → K) (g10_d12 : K → K → K → K → K) (g10_d13 : K → K → K → K → K) (g10_d2 : K → K → K → K → K) (g10_d22 : K → K → K → K → K) (g10_d23 : K → K → K → K → K) (g10_d3 : K → K → K → K → K) (g11 : K → K → K → K → K) (g11_d1 : K → K → K → K → K) (g11_d11 : K → K → K → K → K) (g11_d12 : K → K → K → K → K) (g11_d13 : K → K → K → K → K) (g11_d2 : K → K → K → K → K) (g11_d22 : K → K → K → K → K) (g11_d23 : K → K → K → K → K) (g11_d3 : K → K → K → K → K) (t y0 y1 a0 a1 b bu th thu v0 v1 : K) :
    Gen.adj_gp_i_general_22_ng_out_0_0 g00 g00_d1 g00_d2 g00_d3 g01 g01_d1 g01_d2 g01_d3 g10 g10_d1 g10_d2 g10_d3 g11 g11_d1 g11_d2 g11_d3 t y0 y1 a0 a1 b bu th thu v0 v1
      = gProdY (jet_general_22 f0 f0_d1 f0_d2 f0_d3 f1 f1_d1 f1_d2 f1_d3 g00 g00_d1 g00_d11 g00_d12 g00_d13 g00_d2 g00_d22 g00_d23 g00_d3 g01 g01_d1 g01_d11 g01_d12 g01_d13 g01_d2 g01_d22 g01_d23 g01_d3 g10 g10_d1 g10_d11 g10_d12 g10_d13 g10_d2 g10_d22 g10_d23 g10_d3 g11 g11_d1 g11_d11 g11_d12 g11_d13 g11_d2 g11_d22 g11_d23 g11_d3 t y0 y1 th) ![v0, v1] 0 ∧
    Gen.adj_gp_i_general_22_ng_out_0_1 g00 g00_d1 g00_d2 g00_d3 g01 g01_d1 g01_d2 g01_d3 g10 g10_d1 g10_d2 g10_d3 g11 g11_d1 g11_d2 g11_d3 t y0 y1 a0 a1 b bu th thu v0 v1
      = gProdY (jet_general_22 f0 f0_d1 f0_d2 f0_d3 f1 f1_d1 f1_d2 f1_d3 g00 g00_d1 g00_d11 g00_d12 g00_d13 g00_d2 g00_d22 g00_d23 g00_d3 g01 g01_d1 g01_d11 g01_d12 g01_d13 g01_d2 g01_d22 g01_d23 g01_d3 g10 g10_d1 g10_d11 g10_d12 g10_d13 g10_d2 g10_d22 g10_d23 g10_d3 g11 g11_d1 g11_d11 g11_d12 g11_d13 g11_d2 g11_d22 g11_d23 g11_d3 t y0 y1 th) ![v0, v1] 1 ∧
    Gen.adj_gp_i_general_22_ng_out_0_2 g00 g00_d1 g00_d2 g00_d3 g01 g01_d1 g01_d2 g01_d3 g10 g10_d1 g10_d2 g10_d3 g11 g11_d1 g11_d2 g11_d3 t y0 y1 a0 a1 b bu th thu v0 v1
      = gProdA (jet_general_22 f0 f0_d1 f0_d2 f0_d3 f1 f1_d1 f1_d2 f1_d3 g00 g00_d1 g00_d11 g00_d12 g00_d13 g00_d2 g00_d22 g00_d23 g00_d3 g01 g01_d1 g01_d11 g01_d12 g01_d13 g01_d2 g01_d22 g01_d23 g01_d3 g10 g10_d1 g10_d11 g10_d12 g10_d13 g10_d2 g10_d22 g10_d23 g10_d3 g11 g11_d1 g11_d11 g11_d12 g11_d13 g11_d2 g11_d22 g11_d23 g11_d3 t y0 y1 th) ![a0, a1] ![v0, v1] 0 ∧
    Gen.adj_gp_i_general_22_ng_out_0_3 g00 g00_d1 g00_d2 g00_d3 g01 g01_d1 g01_d2 g01_d3 g10 g10_d1 g10_d2 g10_d3 g11 g11_d1 g11_d2 g11_d3 t y0 y1 a0 a1 b bu th thu v0 v1
      = gProdA (jet_general_22 f0 f0_d1 f0_d2 f0_d3 f1 f1_d1 f1_d2 f1_d3 g00 g00_d1 g00_d11 g00_d12 g00_d13 g00_d2 g00_d22 g00_d23 g00_d3 g01 g01_d1 g01_d11 g01_d12 g01_d13 g01_d2 g01_d22 g01_d23 g01_d3 g10 g10_d1 g10_d11 g10_d12 g10_d13 g10_d2 g10_d22 g10_d23 g10_d3 g11 g11_d1 g11_d11 g11_d12 g11_d13 g11_d2 g11_d22 g11_d23 g11_d3 t y0 y1 th) ![a0, a1] ![v0, v1] 1 ∧
    Gen.adj_gp_i_general_22_ng_out_0_4 g00 g00_d1 g00_d2 g00_d3 g01 g01_d1 g01_d2 g01_d3 g10 g10_d1 g10_d2 g10_d3 g11 g11_d1 g11_d2 g11_d3 t y0 y1 a0 a1 b bu th thu v0 v1
      = gProdTh (jet_general_22 f0 f0_d1 f0_d2 f0_d3 f1 f1_d1 f1_d2 f1_d3 g00 g00_d1 g00_d11 g00_d12 g00_d13 g00_d2 g00_d22 g00_d23 g00_d3 g01 g01_d1 g01_d11 g01_d12 g01_d13 g01_d2 g01_d22 g01_d23 g01_d3 g10 g10_d1 g10_d11 g10_d12 g10_d13 g10_d2 g10_d22 g10_d23 g10_d3 g11 g11_d1 g11_d11 g11_d12 g11_d13 g11_d2 g11_d22 g11_d23 g11_d3 t y0 y1 th) ![a0, a1] ![v0, v1] 0 ∧
    Gen.adj_gp_i_general_22_ng_out_0_5 g00 g00_d1 g00_d2 g00_d3 g01 g01_d1 g01_d2 g01_d3 g10 g10_d1 g10_d2 g10_d3 g11 g11_d1 g11_d2 g11_d3 t y0 y1 a0 a1 b bu th thu v0 v1
      = gProdTh (jet_general_22 f0 f0_d1 f0_d2 f0_d3 f1 f1_d1 f1_d2 f1_d3 g00 g00_d1 g00_d11 g00_d12 g00_d13 g00_d2 g00_d22 g00_d23 g00_d3 g01 g01_d1 g01_d11 g01_d12 g01_d13 g01_d2 g01_d22 g01_d23 g01_d3 g10 g10_d1 g10_d11 g10_d12 g10_d13 g10_d2 g10_d22 g10_d23 g10_d3 g11 g11_d1 g11_d11 g11_d12 g11_d13 g11_d2 g11_d22 g11_d23 g11_d3 t y0 y1 th) ![a0, a1] ![v0, v1] 1 := by
  refine ⟨?_, ?_, ?_, ?_, ?_, ?_⟩ <;>
  simp [Gen.adj_gp_i_general_22_ng_out_0_0, Gen.adj_gp_i_general_22_ng_out_0_1, Gen.adj_gp_i_general_22_ng_out_0_2, Gen.adj_gp_i_general_22_ng_out_0_3, Gen.adj_gp_i_general_22_ng_out_0_4, Gen.adj_gp_i_general_22_ng_out_0_5, jet_general_22, stratDriftY, stratDriftA, stratDriftTh, itoDriftY, itoDriftA, itoDriftTh, gProdY, gProdA, gProdTh, gdgY, gdgA, gdgTh, driftY, driftA, driftTh, diffY, diffA, diffTh, itoCorr, itoCorrY, itoCorrTh, fStrat, fStratY, fStratTh, colCorrY, colCorrA, colCorrTh, Fin.sum_univ_two, Fin.sum_univ_one, Fin.isValue, Matrix.cons_val_zero, Matrix.cons_val_one, Matrix.cons_val_fin_one, Matrix.head_cons] <;> ring

theorem adj_gp_i_general_22_ng_unused_param_zero (f0 : K → K → K → K → K) (f0_d1 : K → K → K → K → K) (f0_d2 : K → K → K → K → K) (f0_d3 : K → K → K → K → K) (f1 : K → K → K → K → K) (f1_d1 : K → K → K → K → K) (f1_d2 : K → K → K → K → K) (f1_d3 : K → K → K → K → K) (g00 : K → K → K → K → K) (g00_d1 : K → K → K → K → K) (g00_d11 : K → K → K → K → K) (g00_d12 : K → K → K → K → K) (g00_d13 : K → K → K → K → K) (g00_d2 : K → K → K → K → K) (g00_d22 : K → K → K → K → K) (g00_d23 : K → K → K → K → K) (g00_d3 : K → K → K → K → K) (g01 : K → K → K → K → K) (g01_d1 : K → K → K → K → K) (g01_d11 : K → K → K → K → K) (g01_d12 : K → K → K → K → K) (g01_d13 : K → K → K → K → K) (g01_d2 : K → K → K → K → K) (g01_d22 : K → K → K → K → K) (g01_d23 : K → K → K → K → K) (g01_d3 : K → K → K → K → K) (g10 : K → K → K → K → K) (g10_d1 : K → K → K → K → K) (g10_d11 : K → K → K → K → K) (g10_d12 : K → K → K → K → K) (g10_d13 : K → K → K → K → K) (g10_d2 : K → K → K → K → K) (g10_d22 : K → K → K → K → K) (g10_d23 : K → K → K → K → K) (g10_d3 : K → K → K → K → K) (g11 : K → K → K → K → K) (g11_d1 : K → K → K → K → K) (g11_d11 : K → K → K → K → K) (g11_d12 : K → K → K → K → K) (g11_d13 : K → K → K → K → K) (g11_d2 : K → K → K → K → K) (g11_d22 : K → K → K → K → K) (g11_d23 : K → K → K → K → K) (g11_d3 : K → K → K → K → K) (t y0 y1 a0 a1 b bu th thu v0 v1 : K) :
    Gen.adj_gp_i_general_22_ng_out_0_5 g00 g00_d1 g00_d2 g00_d3 g01 g01_d1 g01_d2 g01_d3 g10 g10_d1 g10_d2 g10_d3 g11 g11_d1 g11_d2 g11_d3 t y0 y1 a0 a1 b bu th thu v0 v1 = 0 := by
  simp [Gen.adj_gp_i_general_22_ng_out_0_5]

theorem adj_gp_i_general_22_ng_graph (f0 : K → K → K → K → K) (f0_d1 : K → K → K → K → K) (f0_d2 : K → K → K → K → K) (f0_d3 : K → K → K → K → K) (f1 : K → K → K → K → K) (f1_d1 : K → K → K → K → K) (f1_d2 : K → K → K → K → K) (f1_d3 : K → K → K → K → K) (g00 : K → K → K → K → K) (g00_d1 : K → K → K → K → K) (g00_d11 : K → K → K → K → K) (g00_d12 : K → K → K → K → K) (g00_d13 : K → K → K → K → K) (g00_d2 : K → K → K → K → K) (g00_d22 : K → K → K → K → K) (g00_d23 : K → K → K → K → K) (g00_d3 : K → K → K → K → K) (g01 : K → K → K → K → K) (g01_d1 : K → K → K → K → K) (g01_d11 : K → K → K → K → K) (g01_d12 : K → K → K → K → K) (g01_d13 : K → K → K → K → K) (g01_d2 : K → K → K → K → K) (g01_d22 : K → K → K → K → K) (g01_d23 : K → K → K → K → K) (g01_d3 : K → K → K → K → K) (g10 : K → K → K → K → K) (g10_d1 : K → K → K → K → K) (g10_d11 : K → K → K → K → K) (g10_d12 : K → K → K → K → K) (g10_d13 : K → K → K → K → K) (g10_d2 : K → K → K → K → K) (g10_d22 : K → K → K → K → K) (g10_d23 : K → K → K → K → K) (g10_d3 : K → K → K → K → K) (g11 : K → K → K → K → K) (g11_d1 : K → K → K → K → K) (g11_d11 : K → K → K → K → K) (g11_d12 : K → K → K → K → K) (g11_d13 : K → K → K → K → K) (g11_d2 : K → K → K → K → K) (g11_d22 : K → K → K → K → K) (g11_d23 : K → K → K → K → K) (g11_d3 : K → K → K → K → K) (t y0 y1 a0 a1 b bu th thu v0 v1 : K) :
    Gen.adj_gp_i_general_22_ng_rg_out g00 g00_d1 g00_d2 g00_d3 g01 g01_d1 g01_d2 g01_d3 g10 g10_d1 g10_d2 g10_d3 g11 g11_d1 g11_d2 g11_d3 t y0 y1 a0 a1 b bu th thu v0 v1 = 0 ∧
    Gen.adj_gp_i_general_22_ng_leaf_out g00 g00_d1 g00_d2 g00_d3 g01 g01_d1 g01_d2 g01_d3 g10 g10_d1 g10_d2 g10_d3 g11 g11_d1 g11_d2 g11_d3 t y0 y1 a0 a1 b bu th thu v0 v1 = 1 ∧
    Gen.adj_gp_i_general_22_ng_rg_z_after g00 g00_d1 g00_d2 g00_d3 g01 g01_d1 g01_d2 g01_d3 g10 g10_d1 g10_d2 g10_d3 g11 g11_d1 g11_d2 g11_d3 t y0 y1 a0 a1 b bu th thu v0 v1 = 0 ∧
    Gen.adj_gp_i_general_22_ng_leaf_z_after g00 g00_d1 g00_d2 g00_d3 g01 g01_d1 g01_d2 g01_d3 g10 g10_d1 g10_d2 g10_d3 g11 g11_d1 g11_d2 g11_d3 t y0 y1 a0 a1 b bu th thu v0 v1 = 1 := by
  refine ⟨?_, ?_, ?_, ?_⟩ <;> simp only [Gen.adj_gp_i_general_22_ng_rg_out, Gen.adj_gp_i_general_22_ng_leaf_out, Gen.adj_gp_i_general_22_ng_rg_z_after, Gen.adj_gp_i_general_22_ng_leaf_z_after]

theorem adj_gp_i_general_22_en_spec (f0 : K → K → K → K → K) (f0_d1 : K → K → K → K → K) (f0_d2 : K → K → K → K → K) (f0_d3 : K → K → K → K → K) (f1 : K → K → K → K → K) (f1_d1 : K → K → K → K → K) (f1_d2 : K → K → K → K → K) (f1_d3 : K → K → K → K → K) (g00 : K → K → K → K → K) (g00_d1 : K → K → K → K → K) (g00_d11 : K → K → K → K → K) (g00_d12 : K → K → K → K → K) (g00_d13 : K → K → K → K → K) (g00_d2 : K → K → K → K → K) (g00_d22 : K → K → K → K → K) (g00_d23 : K → K → K → K → K) (g00_d3 : K → K → K → K → K) (g01 : K → K → K → K → K) (g01_d1 : K → K → K → K → K) (g01_d11 : K → K → K → K → K) (g01_d12 : K → K → K → K → K) (g01_d13 : K → K → K → K → K) (g01_d2 : K → K → K → K → K) (g01_d22 : K → K → K → K → K) (g01_d23 : K → K → K → K → K) (g01_d3 : K → K → K → K → K) (g10 : K → K → K → K → K) (g10_d1 : K → K → K → K → K) (g10_d11 : K → K → K → K → K) (g10_d12 : K → K → K → K → K) (g10_d13 : K → K → K → K → K) (g10_d2 : K → K → K → K → K) (g10_d22 : K → K → K → K → K) (g10_d23 : K → K → K → K → K) (g10_d3 : K → K → K → K → K) (g11 : K → K → K → K → K) (g11_d1 : K → K → K → K → K) (g11_d11 : K → K → K → K → K) (g11_d12 : K → K → K → K → K) (g11_d13 : K → K → K → K → K) (g11_d2 : K → K → K → K → K) (g11_d22 : K → K → K → K → K) (g11_d23 : K → K → K → K → K) (g11_d3 : K → K → K → K → K) (t y0 y1 a0 a1 b bu th thu v0 v1 : K) :
    Gen.adj_gp_i_general_22_en_out_0_0 g00 g00_d1 g00_d2 g00_d3 g01 g01_d1 g01_d2 g01_d3 g10 g10_d1 g10_d2 g10_d3 g11 g11_d1 g11_d2 g11_d3 t y0 y1 a0 a1 b bu th thu v0 v1
      = gProdY (jet_general_22 f0 f0_d1 f0_d2 f0_d3 f1 f1_d1 f1_d2 f1_d3 g00 g00_d1 g00_d11 g00_d12 g00_d13 g00_d2 g00_d22 g00_d23 g00_d3 g01 g01_d1 g01_d11 g01_d12 g01_d13 g01_d2 g01_d22 g01_d23 g01_d3 g10 g10_d1 g10_d11 g10_d12 g10_d13 g10_d2 g10_d22 g10_d23 g10_d3 g11 g11_d1 g11_d11 g11_d12 g11_d13 g11_d2 g11_d22 g11_d23 g11_d3 t y0 y1 th) ![v0, v1] 0 ∧
    Gen.adj_gp_i_general_22_en_out_0_1 g00 g00_d1 g00_d2 g00_d3 g01 g01_d1 g01_d2 g01_d3 g10 g10_d1 g10_d2 g10_d3 g11 g11_d1 g11_d2 g11_d3 t y0 y1 a0 a1 b bu th thu v0 v1
      = gProdY (jet_general_22 f0 f0_d1 f0_d2 f0_d3 f1 f1_d1 f1_d2 f1_d3 g00 g00_d1 g00_d11 g00_d12 g00_d13 g00_d2 g00_d22 g00_d23 g00_d3 g01 g01_d1 g01_d11 g01_d12 g01_d13 g01_d2 g01_d22 g01_d23 g01_d3 g10 g10_d1 g10_d11 g10_d12 g10_d13 g10_d2 g10_d22 g10_d23 g10_d3 g11 g11_d1 g11_d11 g11_d12 g11_d13 g11_d2 g11_d22 g11_d23 g11_d3 t y0 y1 th) ![v0, v1] 1 ∧
    Gen.adj_gp_i_general_22_en_out_0_2 g00 g00_d1 g00_d2 g00_d3 g01 g01_d1 g01_d2 g01_d3 g10 g10_d1 g10_d2 g10_d3 g11 g11_d1 g11_d2 g11_d3 t y0 y1 a0 a1 b bu th thu v0 v1
      = gProdA (jet_general_22 f0 f0_d1 f0_d2 f0_d3 f1 f1_d1 f1_d2 f1_d3 g00 g00_d1 g00_d11 g00_d12 g00_d13 g00_d2 g00_d22 g00_d23 g00_d3 g01 g01_d1 g01_d11 g01_d12 g01_d13 g01_d2 g01_d22 g01_d23 g01_d3 g10 g10_d1 g10_d11 g10_d12 g10_d13 g10_d2 g10_d22 g10_d23 g10_d3 g11 g11_d1 g11_d11 g11_d12 g11_d13 g11_d2 g11_d22 g11_d23 g11_d3 t y0 y1 th) ![a0, a1] ![v0, v1] 0 ∧
    Gen.adj_gp_i_general_22_en_out_0_3 g00 g00_d1 g00_d2 g00_d3 g01 g01_d1 g01_d2 g01_d3 g10 g10_d1 g10_d2 g10_d3 g11 g11_d1 g11_d2 g11_d3 t y0 y1 a0 a1 b bu th thu v0 v1
      = gProdA (jet_general_22 f0 f0_d1 f0_d2 f0_d3 f1 f1_d1 f1_d2 f1_d3 g00 g00_d1 g00_d11 g00_d12 g00_d13 g00_d2 g00_d22 g00_d23 g00_d3 g01 g01_d1 g01_d11 g01_d12 g01_d13 g01_d2 g01_d22 g01_d23 g01_d3 g10 g10_d1 g10_d11 g10_d12 g10_d13 g10_d2 g10_d22 g10_d23 g10_d3 g11 g11_d1 g11_d11 g11_d12 g11_d13 g11_d2 g11_d22 g11_d23 g11_d3 t y0 y1 th) ![a0, a1] ![v0, v1] 1 ∧
    Gen.adj_gp_i_general_22_en_out_0_4 g00 g00_d1 g00_d2 g00_d3 g01 g01_d1 g01_d2 g01_d3 g10 g10_d1 g10_d2 g10_d3 g11 g11_d1 g11_d2 g11_d3 t y0 y1 a0 a1 b bu th thu v0 v1
      = gProdTh (jet_general_22 f0 f0_d1 f0_d2 f0_d3 f1 f1_d1 f1_d2 f1_d3 g00 g00_d1 g00_d11 g00_d12 g00_d13 g00_d2 g00_d22 g00_d23 g00_d3 g01 g01_d1 g01_d11 g01_d12 g01_d13 g01_d2 g01_d22 g01_d23 g01_d3 g10 g10_d1 g10_d11 g10_d12 g10_d13 g10_d2 g10_d22 g10_d23 g10_d3 g11 g11_d1 g11_d11 g11_d12 g11_d13 g11_d2 g11_d22 g11_d23 g11_d3 t y0 y1 th) ![a0, a1] ![v0, v1] 0 ∧
    Gen.adj_gp_i_general_22_en_out_0_5 g00 g00_d1 g00_d2 g00_d3 g01 g01_d1 g01_d2 g01_d3 g10 g10_d1 g10_d2 g10_d3 g11 g11_d1 g11_d2 g11_d3 t y0 y1 a0 a1 b bu th thu v0 v1
      = gProdTh (jet_general_22 f0 f0_d1 f0_d2 f0_d3 f1 f1_d1 f1_d2 f1_d3 g00 g00_d1 g00_d11 g00_d12 g00_d13 g00_d2 g00_d22 g00_d23 g00_d3 g01 g01_d1 g01_d11 g01_d12 g01_d13 g01_d2 g01_d22 g01_d23 g01_d3 g10 g10_d1 g10_d11 g10_d12 g10_d13 g10_d2 g10_d22 g10_d23 g10_d3 g11 g11_d1 g11_d11 g11_d12 g11_d13 g11_d2 g11_d22 g11_d23 g11_d3 t y0 y1 th) ![a0, a1] ![v0, v1] 1 := by
  refine ⟨?_, ?_, ?_, ?_, ?_, ?_⟩ <;>
  simp [Gen.adj_gp_i_general_22_en_out_0_0, Gen.adj_gp_i_general_22_en_out_0_1, Gen.adj_gp_i_general_22_en_out_0_2, Gen.adj_gp_i_general_22_en_out_0_3, Gen.adj_gp_i_general_22_en_out_0_4, Gen.adj_gp_i_general_22_en_out_0_5, jet_general_22, stratDriftY, stratDriftA, stratDriftTh, itoDriftY, itoDriftA, itoDriftTh, gProdY, gProdA, gProdTh, gdgY, gdgA, gdgTh, driftY, driftA, driftTh, diffY, diffA, diffTh, itoCorr, itoCorrY, itoCorrTh, fStrat, fStratY, fStratTh, colCorrY, colCorrA, colCorrTh, Fin.sum_univ_two, Fin.sum_univ_one, Fin.isValue, Matrix.cons_val_zero, Matrix.cons_val_one, Matrix.cons_val_fin_one, Matrix.head_cons] <;> ring

theorem adj_gp_i_general_22_en_unused_param_zero (f0 : K → K → K → K → K) (f0_d1 : K → K → K → K → K) (f0_d2 : K → K → K → K → K) (f0_d3 : K → K → K → K → K) (f1 : K → K → K → K → K) (f1_d1 : K → K → K → K → K) (f1_d2 : K → K → K → K → K) (f1_d3 : K → K → K → K → K) (g00 : K → K → K → K → K) (g00_d1 : K → K → K → K → K) (g00_d11 : K → K → K → K → K) (g00_d12 : K → K → K → K → K) (g00_d13 : K → K → K → K → K) (g00_d2 : K → K → K → K → K) (g00_d22 : K → K → K → K → K) (g00_d23 : K → K → K → K → K) (g00_d3 : K → K → K → K → K) (g01 : K → K → K → K → K) (g01_d1 : K → K → K → K → K) (g01_d11 : K → K → K → K → K) (g01_d12 : K → K → K → K → K) (g01_d13 : K → K → K → K → K) (g01_d2 : K → K → K → K → K) (g01_d22 : K → K → K → K → K) (g01_d23 : K → K → K → K → K) (g01_d3 : K → K → K → K → K) (g10 : K → K → K → K → K) (g10_d1 : K → K → K → K → K) (g10_d11 : K → K → K → K → K) (g10_d12 : K → K → K → K → K) (g10_d13 : K → K → K → K → K) (g10_d2 : K → K → K → K → K) (g10_d22 : K → K → K → K → K) (g10_d23 : K → K → K → K → K) (g10_d3 : K → K → K → K → K) (g11 : K → K → K → K → K) (g11_d1 : K → K → K → K → K) (g11_d11 : K → K → K → K → K) (g11_d12 : K → K → K → K → K) (g11_d13 : K → K → K → K → K) (g11_d2 : K → K → K → K → K) (g11_d22 : K → K → K → K → K) (g11_d23 : K → K → K → K → K) (g11_d3 : K → K → K → K → K) (t y0 y1 a0 a1 b bu th thu v0 v1 : K) :
    Gen.adj_gp_i_general_22_en_out_0_5 g00 g00_d1 g00_d2 g00_d3 g01 g01_d1 g01_d2 g01_d3 g10 g10_d1 g10_d2 g10_d3 g11 g11_d1 g11_d2 g11_d3 t y0 y1 a0 a1 b bu th thu v0 v1 = 0 := by
  simp [Gen.adj_gp_i_general_22_en_out_0_5]

theorem adj_gp_i_general_22_en_graph (f0 : K → K → K → K → K) (f0_d1 : K → K → K → K → K) (f0_d2 : K → K → K → K → K) (f0_d3 : K → K → K → K → K) (f1 : K → K → K → K → K) (f1_d1 : K → K → K → K → K) (f1_d2 : K → K → K → K → K) (f1_d3 : K → K → K → K → K) (g00 : K → K → K → K → K) (g00_d1 : K → K → K → K → K) (g00_d11 : K → K → K → K → K) (g00_d12 : K → K → K → K → K) (g00_d13 : K → K → K → K → K) (g00_d2 : K → K → K → K → K) (g00_d22 : K → K → K → K → K) (g00_d23 : K → K → K → K → K) (g00_d3 : K → K → K → K → K) (g01 : K → K → K → K → K) (g01_d1 : K → K → K → K → K) (g01_d11 : K → K → K → K → K) (g01_d12 : K → K → K → K → K) (g01_d13 : K → K → K → K → K) (g01_d2 : K → K → K → K → K) (g01_d22 : K → K → K → K → K) (g01_d23 : K → K → K → K → K) (g01_d3 : K → K → K → K → K) (g10 : K → K → K → K → K) (g10_d1 : K → K → K → K → K) (g10_d11 : K → K → K → K → K) (g10_d12 : K → K → K → K → K) (g10_d13 : K → K → K → K → K) (g10_d2 : K → K → K → K → K) (g10_d22 : K → K → K → K → K) (g10_d23 : K → K → K → K → K) (g10_d3 : K → K → K → K → K) (g11 : K → K → K → K → K) (g11_d1 : K → K → K → K → K) (g11_d11 : K → K → K → K → K) (g11_d12 : K → K → K → K → K) (g11_d13 : K → K → K → K → K) (g11_d2 : K → K → K → K → K) (g11_d22 : K → K → K → K → K) (g11_d23 : K → K → K → K → K) (g11_d3 : K → K → K → K → K) (t y0 y1 a0 a1 b bu th thu v0 v1 : K) :
    Gen.adj_gp_i_general_22_en_rg_out g00 g00_d1 g00_d2 g00_d3 g01 g01_d1 g01_d2 g01_d3 g10 g10_d1 g10_d2 g10_d3 g11 g11_d1 g11_d2 g11_d3 t y0 y1 a0 a1 b bu th thu v0 v1 = 1 ∧
    Gen.adj_gp_i_general_22_en_leaf_out g00 g00_d1 g00_d2 g00_d3 g01 g01_d1 g01_d2 g01_d3 g10 g10_d1 g10_d2 g10_d3 g11 g11_d1 g11_d2 g11_d3 t y0 y1 a0 a1 b bu th thu v0 v1 = 0 ∧
    Gen.adj_gp_i_general_22_en_rg_z_after g00 g00_d1 g00_d2 g00_d3 g01 g01_d1 g01_d2 g01_d3 g10 g10_d1 g10_d2 g10_d3 g11 g11_d1 g11_d2 g11_d3 t y0 y1 a0 a1 b bu th thu v0 v1 = 1 ∧
    Gen.adj_gp_i_general_22_en_leaf_z_after g00 g00_d1 g00_d2 g00_d3 g01 g01_d1 g01_d2 g01_d3 g10 g10_d1 g10_d2 g10_d3 g11 g11_d1 g11_d2 g11_d3 t y0 y1 a0 a1 b bu th thu v0 v1 = 1 := by
  refine ⟨?_, ?_, ?_, ?_⟩ <;> simp only [Gen.adj_gp_i_general_22_en_rg_out, Gen.adj_gp_i_general_22_en_leaf_out, Gen.adj_gp_i_general_22_en_rg_z_after, Gen.adj_gp_i_general_22_en_leaf_z_after]

theorem adj_fgp_i_general_22_ng_unused_param_zero (f0 : K → K → K → K → K) (f0_d1 : K → K → K → K → K) (f0_d2 : K → K → K → K → K) (f0_d3 : K → K → K → K → K) (f1 : K → K → K → K → K) (f1_d1 : K → K → K → K → K) (f1_d2 : K → K → K → K → K) (f1_d3 : K → K → K → K → K) (g00 : K → K → K → K → K) (g00_d1 : K → K → K → K → K) (g00_d11 : K → K → K → K → K) (g00_d12 : K → K → K → K → K) (g00_d13 : K → K → K → K → K) (g00_d2 : K → K → K → K → K) (g00_d22 : K → K → K → K → K) (g00_d23 : K → K → K → K → K) (g00_d3 : K → K → K → K → K) (g01 : K → K → K → K → K) (g01_d1 : K → K → K → K → K) (g01_d11 : K → K → K → K → K) (g01_d12 : K → K → K → K → K) (g01_d13 : K → K → K → K → K) (g01_d2 : K → K → K → K → K) (g01_d22 : K → K → K → K → K) (g01_d23 : K → K → K → K → K) (g01_d3 : K → K → K → K → K) (g10 : K → K → K → K → K) (g10_d1 : K → K → K → K → K) (g10_d11 : K → K → K → K → K) (g10_d12 : K → K → K → K → K) (g10_d13 : K → K → K → K → K) (g10_d2 : K → K → K → K → K) (g10_d22 : K → K → K → K → K) (g10_d23 : K → K → K → K → K) (g10_d3 : K → K → K → K → K) (g11 : K → K → K → K → K) (g11_d1 : K → K → K → K → K) (g11_d11 : K → K → K → K → K) (g11_d12 : K → K → K → K → K) (g11_d13 : K → K → K → K → K) (g11_d2 : K → K → K → K → K) (g11_d22 : K → K → K → K → K) (g11_d23 : K → K → K → K → K) (g11_d3 : K → K → K → K → K) (t y0 y1 a0 a1 b bu th thu v0 v1 : K) :
    Gen.adj_fgp_i_general_22_ng_f_0_5 f0 f0_d1 f0_d2 f0_d3 f1 f1_d1 f1_d2 f1_d3 g00 g00_d1 g00_d11 g00_d12 g00_d13 g00_d2 g00_d22 g00_d23 g00_d3 g01 g01_d1 g01_d11 g01_d12 g01_d13 g01_d2 g01_d22 g01_d23 g01_d3 g10 g10_d1 g10_d11 g10_d12 g10_d13 g10_d2 g10_d22 g10_d23 g10_d3 g11 g11_d1 g11_d11 g11_d12 g11_d13 g11_d2 g11_d22 g11_d23 g11_d3 t y0 y1 a0 a1 b bu th thu v0 v1 = 0 ∧
    Gen.adj_fgp_i_general_22_ng_gp_0_5 f0 f0_d1 f0_d2 f0_d3 f1 f1_d1 f1_d2 f1_d3 g00 g00_d1 g00_d11 g00_d12 g00_d13 g00_d2 g00_d22 g00_d23 g00_d3 g01 g01_d1 g01_d11 g01_d12 g01_d13 g01_d2 g01_d22 g01_d23 g01_d3 g10 g10_d1 g10_d11 g10_d12 g10_d13 g10_d2 g10_d22 g10_d23 g10_d3 g11 g11_d1 g11_d11 g11_d12 g11_d13 g11_d2 g11_d22 g11_d23 g11_d3 t y0 y1 a0 a1 b bu th thu v0 v1 = 0 := by
  refine ⟨?_, ?_⟩ <;> simp [Gen.adj_fgp_i_general_22_ng_f_0_5, Gen.adj_fgp_i_general_22_ng_gp_0_5]

theorem adj_fgp_i_general_22_ng_pair (f0 : K → K → K → K → K) (f0_d1 : K → K → K → K → K) (f0_d2 : K → K → K → K → K) (f0_d3 : K → K → K → K → K) (f1 : K → K → K → K → K) (f1_d1 : K → K → K → K → K) (f1_d2 : K → K → K → K → K) (f1_d3 : K → K → K → K → K) (g00 : K → K → K → K → K) (g00_d1 : K → K → K → K → K) (g00_d11 : K → K → K → K → K) (g00_d12 : K → K → K → K → K) (g00_d13 : K → K → K → K → K) (g00_d2 : K → K → K → K → K) (g00_d22 : K → K → K → K → K) (g00_d23 : K → K → K → K → K) (g00_d3 : K → K → K → K → K) (g01 : K → K → K → K → K) (g01_d1 : K → K → K → K → K) (g01_d11 : K → K → K → K → K) (g01_d12 : K → K → K → K → K) (g01_d13 : K → K → K → K → K) (g01_d2 : K → K → K → K → K) (g01_d22 : K → K → K → K → K) (g01_d23 : K → K → K → K → K) (g01_d3 : K → K → K → K → K) (g10 : K → K → K → K → K) (g10_d1 : K → K → K → K → K) (g10_d11 : K → K → K → K → K) (g10_d12 : K → K → K → K → K) (g10_d13 : K → K → K → K → K) (g10_d2 : K → K → K → K → K) (g10_d22 : K → K → K → K → K) (g10_d23 : K → K → K → K → K) (g10_d3 : K → K → K → K → K) (g11 : K → K → K → K → K) (g11_d1 : K → K → K → K → K) (g11_d11 : K → K → K → K → K) (g11_d12 : K → K → K → K → K) (g11_d13 : K → K → K → K → K) (g11_d2 : K → K → K → K → K) (g11_d22 : K → K → K → K → K) (g11_d23 : K → K → K → K → K) (g11_d3 : K → K → K → K → K) (t y0 y1 a0 a1 b bu th thu v0 v1 : K) :
    Gen.adj_fgp_i_general_22_ng_f_0_0 f0 f0_d1 f0_d2 f0_d3 f1 f1_d1 f1_d2 f1_d3 g00 g00_d1 g00_d11 g00_d12 g00_d13 g00_d2 g00_d22 g00_d23 g00_d3 g01 g01_d1 g01_d11 g01_d12 g01_d13 g01_d2 g01_d22 g01_d23 g01_d3 g10 g10_d1 g10_d11 g10_d12 g10_d13 g10_d2 g10_d22 g10_d23 g10_d3 g11 g11_d1 g11_d11 g11_d12 g11_d13 g11_d2 g11_d22 g11_d23 g11_d3 t y0 y1 a0 a1 b bu th thu v0 v1
      = Gen.adj_f_i_general_22_ng_out_0_0 f0 f0_d1 f0_d2 f0_d3 f1 f1_d1 f1_d2 f1_d3 g00 g00_d1 g00_d11 g00_d12 g00_d13 g00_d2 g00_d22 g00_d23 g00_d3 g01 g01_d1 g01_d11 g01_d12 g01_d13 g01_d2 g01_d22 g01_d23 g01_d3 g10 g10_d1 g10_d11 g10_d12 g10_d13 g10_d2 g10_d22 g10_d23 g10_d3 g11 g11_d1 g11_d11 g11_d12 g11_d13 g11_d2 g11_d22 g11_d23 g11_d3 t y0 y1 a0 a1 b bu th thu ∧
    Gen.adj_fgp_i_general_22_ng_f_0_1 f0 f0_d1 f0_d2 f0_d3 f1 f1_d1 f1_d2 f1_d3 g00 g00_d1 g00_d11 g00_d12 g00_d13 g00_d2 g00_d22 g00_d23 g00_d3 g01 g01_d1 g01_d11 g01_d12 g01_d13 g01_d2 g01_d22 g01_d23 g01_d3 g10 g10_d1 g10_d11 g10_d12 g10_d13 g10_d2 g10_d22 g10_d23 g10_d3 g11 g11_d1 g11_d11 g11_d12 g11_d13 g11_d2 g11_d22 g11_d23 g11_d3 t y0 y1 a0 a1 b bu th thu v0 v1
      = Gen.adj_f_i_general_22_ng_out_0_1 f0 f0_d1 f0_d2 f0_d3 f1 f1_d1 f1_d2 f1_d3 g00 g00_d1 g00_d11 g00_d12 g00_d13 g00_d2 g00_d22 g00_d23 g00_d3 g01 g01_d1 g01_d11 g01_d12 g01_d13 g01_d2 g01_d22 g01_d23 g01_d3 g10 g10_d1 g10_d11 g10_d12 g10_d13 g10_d2 g10_d22 g10_d23 g10_d3 g11 g11_d1 g11_d11 g11_d12 g11_d13 g11_d2 g11_d22 g11_d23 g11_d3 t y0 y1 a0 a1 b bu th thu ∧
    Gen.adj_fgp_i_general_22_ng_f_0_2 f0 f0_d1 f0_d2 f0_d3 f1 f1_d1 f1_d2 f1_d3 g00 g00_d1 g00_d11 g00_d12 g00_d13 g00_d2 g00_d22 g00_d23 g00_d3 g01 g01_d1 g01_d11 g01_d12 g01_d13 g01_d2 g01_d22 g01_d23 g01_d3 g10 g10_d1 g10_d11 g10_d12 g10_d13 g10_d2 g10_d22 g10_d23 g10_d3 g11 g11_d1 g11_d11 g11_d12 g11_d13 g11_d2 g11_d22 g11_d23 g11_d3 t y0 y1 a0 a1 b bu th thu v0 v1
      = Gen.adj_f_i_general_22_ng_out_0_2 f0 f0_d1 f0_d2 f0_d3 f1 f1_d1 f1_d2 f1_d3 g00 g00_d1 g00_d11 g00_d12 g00_d13 g00_d2 g00_d22 g00_d23 g00_d3 g01 g01_d1 g01_d11 g01_d12 g01_d13 g01_d2 g01_d22 g01_d23 g01_d3 g10 g10_d1 g10_d11 g10_d12 g10_d13 g10_d2 g10_d22 g10_d23 g10_d3 g11 g11_d1 g11_d11 g11_d12 g11_d13 g11_d2 g11_d22 g11_d23 g11_d3 t y0 y1 a0 a1 b bu th thu ∧
    Gen.adj_fgp_i_general_22_ng_f_0_3 f0 f0_d1 f0_d2 f0_d3 f1 f1_d1 f1_d2 f1_d3 g00 g00_d1 g00_d11 g00_d12 g00_d13 g00_d2 g00_d22 g00_d23 g00_d3 g01 g01_d1 g01_d11 g01_d12 g01_d13 g01_d2 g01_d22 g01_d23 g01_d3 g10 g10_d1 g10_d11 g10_d12 g10_d13 g10_d2 g10_d22 g10_d23 g10_d3 g11 g11_d1 g11_d11 g11_d12 g11_d13 g11_d2 g11_d22 g11_d23 g11_d3 t y0 y1 a0 a1 b bu th thu v0 v1
      = Gen.adj_f_i_general_22_ng_out_0_3 f0 f0_d1 f0_d2 f0_d3 f1 f1_d1 f1_d2 f1_d3 g00 g00_d1 g00_d11 g00_d12 g00_d13 g00_d2 g00_d22 g00_d23 g00_d3 g01 g01_d1 g01_d11 g01_d12 g01_d13 g01_d2 g01_d22 g01_d23 g01_d3 g10 g10_d1 g10_d11 g10_d12 g10_d13 g10_d2 g10_d22 g10_d23 g10_d3 g11 g11_d1 g11_d11 g11_d12 g11_d13 g11_d2 g11_d22 g11_d23 g11_d3 t y0 y1 a0 a1 b bu th thu ∧
    Gen.adj_fgp_i_general_22_ng_f_0_4 f0 f0_d1 f0_d2 f0_d3 f1 f1_d1 f1_d2 f1_d3 g00 g00_d1 g00_d11 g00_d12 g00_d13 g00_d2 g00_d22 g00_d23 g00_d3 g01 g01_d1 g01_d11 g01_d12 g01_d13 g01_d2 g01_d22 g01_d23 g01_d3 g10 g10_d1 g10_d11 g10_d12 g10_d13 g10_d2 g10_d22 g10_d23 g10_d3 g11 g11_d1 g11_d11 g11_d12 g11_d13 g11_d2 g11_d22 g11_d23 g11_d3 t y0 y1 a0 a1 b bu th thu v0 v1
      = Gen.adj_f_i_general_22_ng_out_0_4 f0 f0_d1 f0_d2 f0_d3 f1 f1_d1 f1_d2 f1_d3 g00 g00_d1 g00_d11 g00_d12 g00_d13 g00_d2 g00_d22 g00_d23 g00_d3 g01 g01_d1 g01_d11 g01_d12 g01_d13 g01_d2 g01_d22 g01_d23 g01_d3 g10 g10_d1 g10_d11 g10_d12 g10_d13 g10_d2 g10_d22 g10_d23 g10_d3 g11 g11_d1 g11_d11 g11_d12 g11_d13 g11_d2 g11_d22 g11_d23 g11_d3 t y0 y1 a0 a1 b bu th thu ∧
    Gen.adj_fgp_i_general_22_ng_f_0_5 f0 f0_d1 f0_d2 f0_d3 f1 f1_d1 f1_d2 f1_d3 g00 g00_d1 g00_d11 g00_d12 g00_d13 g00_d2 g00_d22 g00_d23 g00_d3 g01 g01_d1 g01_d11 g01_d12 g01_d13 g01_d2 g01_d22 g01_d23 g01_d3 g10 g10_d1 g10_d11 g10_d12 g10_d13 g10_d2 g10_d22 g10_d23 g10_d3 g11 g11_d1 g11_d11 g11_d12 g11_d13 g11_d2 g11_d22 g11_d23 g11_d3 t y0 y1 a0 a1 b bu th thu v0 v1
      = Gen.adj_f_i_general_22_ng_out_0_5 f0 f0_d1 f0_d2 f0_d3 f1 f1_d1 f1_d2 f1_d3 g00 g00_d1 g00_d11 g00_d12 g00_d13 g00_d2 g00_d22 g00_d23 g00_d3 g01 g01_d1 g01_d11 g01_d12 g01_d13 g01_d2 g01_d22 g01_d23 g01_d3 g10 g10_d1 g10_d11 g10_d12 g10_d13 g10_d2 g10_d22 g10_d23 g10_d3 g11 g11_d1 g11_d11 g11_d12 g11_d13 g11_d2 g11_d22 g11_d23 g11_d3 t y0 y1 a0 a1 b bu th thu ∧
    Gen.adj_fgp_i_general_22_ng_gp_0_0 f0 f0_d1 f0_d2 f0_d3 f1 f1_d1 f1_d2 f1_d3 g00 g00_d1 g00_d11 g00_d12 g00_d13 g00_d2 g00_d22 g00_d23 g00_d3 g01 g01_d1 g01_d11 g01_d12 g01_d13 g01_d2 g01_d22 g01_d23 g01_d3 g10 g10_d1 g10_d11 g10_d12 g10_d13 g10_d2 g10_d22 g10_d23 g10_d3 g11 g11_d1 g11_d11 g11_d12 g11_d13 g11_d2 g11_d22 g11_d23 g11_d3 t y0 y1 a0 a1 b bu th thu v0 v1
      = Gen.adj_gp_i_general_22_ng_out_0_0 g00 g00_d1 g00_d2 g00_d3 g01 g01_d1 g01_d2 g01_d3 g10 g10_d1 g10_d2 g10_d3 g11 g11_d1 g11_d2 g11_d3 t y0 y1 a0 a1 b bu th thu v0 v1 ∧
    Gen.adj_fgp_i_general_22_ng_gp_0_1 f0 f0_d1 f0_d2 f0_d3 f1 f1_d1 f1_d2 f1_d3 g00 g00_d1 g00_d11 g00_d12 g00_d13 g00_d2 g00_d22 g00_d23 g00_d3 g01 g01_d1 g01_d11 g01_d12 g01_d13 g01_d2 g01_d22 g01_d23 g01_d3 g10 g10_d1 g10_d11 g10_d12 g10_d13 g10_d2 g10_d22 g10_d23 g10_d3 g11 g11_d1 g11_d11 g11_d12 g11_d13 g11_d2 g11_d22 g11_d23 g11_d3 t y0 y1 a0 a1 b bu th thu v0 v1
      = Gen.adj_gp_i_general_22_ng_out_0_1 g00 g00_d1 g00_d2 g00_d3 g01 g01_d1 g01_d2 g01_d3 g10 g10_d1 g10_d2 g10_d3 g11 g11_d1 g11_d2 g11_d3 t y0 y1 a0 a1 b bu th thu v0 v1 ∧
    Gen.adj_fgp_i_general_22_ng_gp_0_2 f0 f0_d1 f0_d2 f0_d3 f1 f1_d1 f1_d2 f1_d3 g00 g00_d1 g00_d11 g00_d12 g00_d13 g00_d2 g00_d22 g00_d23 g00_d3 g01 g01_d1 g01_d11 g01_d12 g01_d13 g01_d2 g01_d22 g01_d23 g01_d3 g10 g10_d1 g10_d11 g10_d12 g10_d13 g10_d2 g10_d22 g10_d23 g10_d3 g11 g11_d1 g11_d11 g11_d12 g11_d13 g11_d2 g11_d22 g11_d23 g11_d3 t y0 y1 a0 a1 b bu th thu v0 v1
      = Gen.adj_gp_i_general_22_ng_out_0_2 g00 g00_d1 g00_d2 g00_d3 g01 g01_d1 g01_d2 g01_d3 g10 g10_d1 g10_d2 g10_d3 g11 g11_d1 g11_d2 g11_d3 t y0 y1 a0 a1 b bu th thu v0 v1 ∧
    Gen.adj_fgp_i_general_22_ng_gp_0_3 f0 f0_d1 f0_d2 f0_d3 f1 f1_d1 f1_d2 f1_d3 g00 g00_d1 g00_d11 g00_d12 g00_d13 g00_d2 g00_d22 g00_d23 g00_d3 g01 g01_d1 g01_d11 g01_d12 g01_d13 g01_d2 g01_d22 g01_d23 g01_d3 g10 g10_d1 g10_d11 g10_d12 g10_d13 g10_d2 g10_d22 g10_d23 g10_d3 g11 g11_d1 g11_d11 g11_d12 g11_d13 g11_d2 g11_d22 g11_d23 g11_d3 t y0 y1 a0 a1 b bu th thu v0 v1
      = Gen.adj_gp_i_general_22_ng_out_0_3 g00 g00_d1 g00_d2 g00_d3 g01 g01_d1 g01_d2 g01_d3 g10 g10_d1 g10_d2 g10_d3 g11 g11_d1 g11_d2 g11_d3 t y0 y1 a0 a1 b bu th thu v0 v1 ∧
    Gen.adj_fgp_i_general_22_ng_gp_0_4 f0 f0_d1 f0_d2 f0_d3 f1 f1_d1 f1_d2 f1_d3 g00 g00_d1 g00_d11 g00_d12 g00_d13 g00_d2 g00_d22 g00_d23 g00_d3 g01 g01_d1 g01_d11 g01_d12 g01_d13 g01_d2 g01_d22 g01_d23 g01_d3 g10 g10_d1 g10_d11 g10_d12 g10_d13 g10_d2 g10_d22 g10_d23 g10_d3 g11 g11_d1 g11_d11 g11_d12 g11_d13 g11_d2 g11_d22 g11_d23 g11_d3 t y0 y1 a0 a1 b bu th thu v0 v1
      = Gen.adj_gp_i_general_22_ng_out_0_4 g00 g00_d1 g00_d2 g00_d3 g01 g01_d1 g01_d2 g01_d3 g10 g10_d1 g10_d2 g10_d3 g11 g11_d1 g11_d2 g11_d3 t y0 y1 a0 a1 b bu th thu v0 v1 ∧
    Gen.adj_fgp_i_general_22_ng_gp_0_5 f0 f0_d1 f0_d2 f0_d3 f1 f1_d1 f1_d2 f1_d3 g00 g00_d1 g00_d11 g00_d12 g00_d13 g00_d2 g00_d22 g00_d23 g00_d3 g01 g01_d1 g01_d11 g01_d12 g01_d13 g01_d2 g01_d22 g01_d23 g01_d3 g10 g10_d1 g10_d11 g10_d12 g10_d13 g10_d2 g10_d22 g10_d23 g10_d3 g11 g11_d1 g11_d11 g11_d12 g11_d13 g11_d2 g11_d22 g11_d23 g11_d3 t y0 y1 a0 a1 b bu th thu v0 v1
      = Gen.adj_gp_i_general_22_ng_out_0_5 g00 g00_d1 g00_d2 g00_d3 g01 g01_d1 g01_d2 g01_d3 g10 g10_d1 g10_d2 g10_d3 g11 g11_d1 g11_d2 g11_d3 t y0 y1 a0 a1 b bu th thu v0 v1 := by
  refine ⟨?_, ?_, ?_, ?_, ?_, ?_, ?_, ?_, ?_, ?_, ?_, ?_⟩ <;> simp only [Gen.adj_fgp_i_general_22_ng_f_0_0, Gen.adj_f_i_general_22_ng_out_0_0, Gen.adj_fgp_i_general_22_ng_f_0_1, Gen.adj_f_i_general_22_ng_out_0_1, Gen.adj_fgp_i_general_22_ng_f_0_2, Gen.adj_f_i_general_22_ng_out_0_2, Gen.adj_fgp_i_general_22_ng_f_0_3, Gen.adj_f_i_general_22_ng_out_0_3, Gen.adj_fgp_i_general_22_ng_f_0_4, Gen.adj_f_i_general_22_ng_out_0_4, Gen.adj_fgp_i_general_22_ng_f_0_5, Gen.adj_f_i_general_22_ng_out_0_5, Gen.adj_fgp_i_general_22_ng_gp_0_0, Gen.adj_gp_i_general_22_ng_out_0_0, Gen.adj_fgp_i_general_22_ng_gp_0_1, Gen.adj_gp_i_general_22_ng_out_0_1, Gen.adj_fgp_i_general_22_ng_gp_0_2, Gen.adj_gp_i_general_22_ng_out_0_2, Gen.adj_fgp_i_general_22_ng_gp_0_3, Gen.adj_gp_i_general_22_ng_out_0_3, Gen.adj_fgp_i_general_22_ng_gp_0_4, Gen.adj_gp_i_general_22_ng_out_0_4, Gen.adj_fgp_i_general_22_ng_gp_0_5, Gen.adj_gp_i_general_22_ng_out_0_5] <;> ring

theorem adj_fgp_i_general_22_ng_graph (f0 : K → K → K → K → K) (f0_d1 : K → K → K → K → K) (f0_d2 : K → K → K → K → K) (f0_d3 : K → K → K → K → K) (f1 : K → K → K → K → K) (f1_d1 : K → K → K → K → K) (f1_d2 : K → K → K → K → K) (f1_d3 : K → K → K → K → K) (g00 : K → K → K → K → K) (g00_d1 : K → K → K → K → K) (g00_d11 : K → K → K → K → K) (g00_d12 : K → K → K → K → K) (g00_d13 : K → K → K → K → K) (g00_d2 : K → K → K → K → K) (g00_d22 : K → K → K → K → K) (g00_d23 : K → K → K → K → K) (g00_d3 : K → K → K → K → K) (g01 : K → K → K → K → K) (g01_d1 : K → K → K → K → K) (g01_d11 : K → K → K → K → K) (g01_d12 : K → K → K → K → K) (g01_d13 : K → K → K → K → K) (g01_d2 : K → K → K → K → K) (g01_d22 : K → K → K → K → K) (g01_d23 : K → K → K → K → K) (g01_d3 : K → K → K → K → K) (g10 : K → K → K → K → K) (g10_d1 : K → K → K → K → K) (g10_d11 : K → K → K → K → K) (g10_d12 : K → K → K → K → K) (g10_d13 : K → K → K → K → K) (g10_d2 : K → K → K → K → K) (g10_d22 : K → K → K → K → K) (g10_d23 : K → K → K → K → K) (g10_d3 : K → K → K → K → K) (g11 : K → K → K → K → K) (g11_d1 : K → K → K → K → K) (g11_d11 : K → K → K → K → K) (g11_d12 : K → K → K → K → K) (g11_d13 : K → K → K → K → K) (g11_d2 : K → K → K → K → K) (g11_d22 : K → K → K → K → K) (g11_d23 : K → K → K → K → K) (g11_d3 : K → K → K → K → K) (t y0 y1 a0 a1 b bu th thu v0 v1 : K) :
    Gen.adj_fgp_i_general_22_ng_rg_f f0 f0_d1 f0_d2 f0_d3 f1 f1_d1 f1_d2 f1_d3 g00 g00_d1 g00_d11 g00_d12 g00_d13 g00_d2 g00_d22 g00_d23 g00_d3 g01 g01_d1 g01_d11 g01_d12 g01_d13 g01_d2 g01_d22 g01_d23 g01_d3 g10 g10_d1 g10_d11 g10_d12 g10_d13 g10_d2 g10_d22 g10_d23 g10_d3 g11 g11_d1 g11_d11 g11_d12 g11_d13 g11_d2 g11_d22 g11_d23 g11_d3 t y0 y1 a0 a1 b bu th thu v0 v1 = 0 ∧
    Gen.adj_fgp_i_general_22_ng_leaf_f f0 f0_d1 f0_d2 f0_d3 f1 f1_d1 f1_d2 f1_d3 g00 g00_d1 g00_d11 g00_d12 g00_d13 g00_d2 g00_d22 g00_d23 g00_d3 g01 g01_d1 g01_d11 g01_d12 g01_d13 g01_d2 g01_d22 g01_d23 g01_d3 g10 g10_d1 g10_d11 g10_d12 g10_d13 g10_d2 g10_d22 g10_d23 g10_d3 g11 g11_d1 g11_d11 g11_d12 g11_d13 g11_d2 g11_d22 g11_d23 g11_d3 t y0 y1 a0 a1 b bu th thu v0 v1 = 1 ∧
    Gen.adj_fgp_i_general_22_ng_rg_gp f0 f0_d1 f0_d2 f0_d3 f1 f1_d1 f1_d2 f1_d3 g00 g00_d1 g00_d11 g00_d12 g00_d13 g00_d2 g00_d22 g00_d23 g00_d3 g01 g01_d1 g01_d11 g01_d12 g01_d13 g01_d2 g01_d22 g01_d23 g01_d3 g10 g10_d1 g10_d11 g10_d12 g10_d13 g10_d2 g10_d22 g10_d23 g10_d3 g11 g11_d1 g11_d11 g11_d12 g11_d13 g11_d2 g11_d22 g11_d23 g11_d3 t y0 y1 a0 a1 b bu th thu v0 v1 = 0 ∧
    Gen.adj_fgp_i_general_22_ng_leaf_gp f0 f0_d1 f0_d2 f0_d3 f1 f1_d1 f1_d2 f1_d3 g00 g00_d1 g00_d11 g00_d12 g00_d13 g00_d2 g00_d22 g00_d23 g00_d3 g01 g01_d1 g01_d11 g01_d12 g01_d13 g01_d2 g01_d22 g01_d23 g01_d3 g10 g10_d1 g10_d11 g10_d12 g10_d13 g10_d2 g10_d22 g10_d23 g10_d3 g11 g11_d1 g11_d11 g11_d12 g11_d13 g11_d2 g11_d22 g11_d23 g11_d3 t y0 y1 a0 a1 b bu th thu v0 v1 = 1 ∧
    Gen.adj_fgp_i_general_22_ng_rg_z_after f0 f0_d1 f0_d2 f0_d3 f1 f1_d1 f1_d2 f1_d3 g00 g00_d1 g00_d11 g00_d12 g00_d13 g00_d2 g00_d22 g00_d23 g00_d3 g01 g01_d1 g01_d11 g01_d12 g01_d13 g01_d2 g01_d22 g01_d23 g01_d3 g10 g10_d1 g10_d11 g10_d12 g10_d13 g10_d2 g10_d22 g10_d23 g10_d3 g11 g11_d1 g11_d11 g11_d12 g11_d13 g11_d2 g11_d22 g11_d23 g11_d3 t y0 y1 a0 a1 b bu th thu v0 v1 = 0 ∧
    Gen.adj_fgp_i_general_22_ng_leaf_z_after f0 f0_d1 f0_d2 f0_d3 f1 f1_d1 f1_d2 f1_d3 g00 g00_d1 g00_d11 g00_d12 g00_d13 g00_d2 g00_d22 g00_d23 g00_d3 g01 g01_d1 g01_d11 g01_d12 g01_d13 g01_d2 g01_d22 g01_d23 g01_d3 g10 g10_d1 g10_d11 g10_d12 g10_d13 g10_d2 g10_d22 g10_d23 g10_d3 g11 g11_d1 g11_d11 g11_d12 g11_d13 g11_d2 g11_d22 g11_d23 g11_d3 t y0 y1 a0 a1 b bu th thu v0 v1 = 1 := by
  refine ⟨?_, ?_, ?_, ?_, ?_, ?_⟩ <;> simp only [Gen.adj_fgp_i_general_22_ng_rg_f, Gen.adj_fgp_i_general_22_ng_leaf_f, Gen.adj_fgp_i_general_22_ng_rg_gp, Gen.adj_fgp_i_general_22_ng_leaf_gp, Gen.adj_fgp_i_general_22_ng_rg_z_after, Gen.adj_fgp_i_general_22_ng_leaf_z_after]

theorem adj_fgp_i_general_22_en_unused_param_zero (f0 : K → K → K → K → K) (f0_d1 : K → K → K → K → K) (f0_d2 : K → K → K → K → K) (f0_d3 : K → K → K → K → K) (f1 : K → K → K → K → K) (f1_d1 : K → K → K → K → K) (f1_d2 : K → K → K → K → K) (f1_d3 : K → K → K → K → K) (g00 : K → K → K → K → K) (g00_d1 : K → K → K → K → K) (g00_d11 : K → K → K → K → K) (g00_d12 : K → K → K → K → K) (g00_d13 : K → K → K → K → K) (g00_d2 : K → K → K → K → K) (g00_d22 : K → K → K → K → K) (g00_d23 : K → K → K → K → K) (g00_d3 : K → K → K → K → K) (g01 : K → K → K → K → K) (g01_d1 : K → K → K → K → K) (g01_d11 : K → K → K → K → K) (g01_d12 : K → K → K → K → K) (g01_d13 : K → K → K → K → K) (g01_d2 : K → K → K → K → K) (g01_d22 : K → K → K → K → K) (g01_d23 : K → K → K → K → K) (g01_d3 : K → K → K → K → K) (g10 : K → K → K → K → K) (g10_d1 : K → K → K → K → K) (g10_d11 : K → K → K → K → K) (g10_d12 : K → K → K → K → K) (g10_d13 : K → K → K → K → K) (g10_d2 : K → K → K → K → K) (g10_d22 : K → K → K → K → K) (g10_d23 : K → K → K → K → K) (g10_d3 : K → K → K → K → K) (g11 : K → K → K → K → K) (g11_d1 : K → K → K → K → K) (g11_d11 : K → K → K → K → K) (g11_d12 : K → K → K → K → K) (g11_d13 : K → K → K → K → K) (g11_d2 : K → K → K → K → K) (g11_d22 : K → K → K → K → K) (g11_d23 : K → K → K → K → K) (g11_d3 : K → K → K → K → K) (t y0 y1 a0 a1 b bu th thu v0 v1 : K) :
    Gen.adj_fgp_i_general_22_en_f_0_5 f0 f0_d1 f0_d2 f0_d3 f1 f1_d1 f1_d2 f1_d3 g00 g00_d1 g00_d11 g00_d12 g00_d13 g00_d2 g00_d22 g00_d23 g00_d3 g01 g01_d1 g01_d11 g01_d12 g01_d13 g01_d2 g01_d22 g01_d23 g01_d3 g10 g10_d1 g10_d11 g10_d12 g10_d13 g10_d2 g10_d22 g10_d23 g10_d3 g11 g11_d1 g11_d11 g11_d12 g11_d13 g11_d2 g11_d22 g11_d23 g11_d3 t y0 y1 a0 a1 b bu th thu v0 v1 = 0 ∧
    Gen.adj_fgp_i_general_22_en_gp_0_5 f0 f0_d1 f0_d2 f0_d3 f1 f1_d1 f1_d2 f1_d3 g00 g00_d1 g00_d11 g00_d12 g00_d13 g00_d2 g00_d22 g00_d23 g00_d3 g01 g01_d1 g01_d11 g01_d12 g01_d13 g01_d2 g01_d22 g01_d23 g01_d3 g10 g10_d1 g10_d11 g10_d12 g10_d13 g10_d2 g10_d22 g10_d23 g10_d3 g11 g11_d1 g11_d11 g11_d12 g11_d13 g11_d2 g11_d22 g11_d23 g11_d3 t y0 y1 a0 a1 b bu th thu v0 v1 = 0 := by
  refine ⟨?_, ?_⟩ <;> simp [Gen.adj_fgp_i_general_22_en_f_0_5, Gen.adj_fgp_i_general_22_en_gp_0_5]

theorem adj_fgp_i_general_22_en_pair (f0 : K → K → K → K → K) (f0_d1 : K → K → K → K → K) (f0_d2 : K → K → K → K → K) (f0_d3 : K → K → K → K → K) (f1 : K → K → K → K → K) (f1_d1 : K → K → K → K → K) (f1_d2 : K → K → K → K → K) (f1_d3 : K → K → K → K → K) (g00 : K → K → K → K → K) (g00_d1 : K → K → K → K → K) (g00_d11 : K → K → K → K → K) (g00_d12 : K → K → K → K → K) (g00_d13 : K → K → K → K → K) (g00_d2 : K → K → K → K → K) (g00_d22 : K → K → K → K → K) (g00_d23 : K → K → K → K → K) (g00_d3 : K → K → K → K → K) (g01 : K → K → K → K → K) (g01_d1 : K → K → K → K → K) (g01_d11 : K → K → K → K → K) (g01_d12 : K → K → K → K → K) (g01_d13 : K → K → K → K → K) (g01_d2 : K → K → K → K → K) (g01_d22 : K → K → K → K → K) (g01_d23 : K → K → K → K → K) (g01_d3 : K → K → K → K → K) (g10 : K → K → K → K → K) (g10_d1 : K → K → K → K → K) (g10_d11 : K → K → K → K → K) (g10_d12 : K → K → K → K → K) (g10_d13 : K → K → K → K → K) (g10_d2 : K → K → K → K → K) (g10_d22 : K → K → K → K → K) (g10_d23 : K → K → K → K → K) (g10_d3 : K → K → K → K → K) (g11 : K → K → K → K → K) (g11_d1 : K → K → K → K → K) (g11_d11 : K → K → K → K → K) (g11_d12 : K → K → K → K → K) (g11_d13 : K → K → K → K → K) (g11_d2 : K → K → K → K → K) (g11_d22 : K → K → K → K → K) (g11_d23 : K → K → K → K → K) (g11_d3 : K → K → K → K → K) (t y0 y1 a0 a1 b bu th thu v0 v1 : K) :
    Gen.adj_fgp_i_general_22_en_f_0_0 f0 f0_d1 f0_d2 f0_d3 f1 f1_d1 f1_d2 f1_d3 g00 g00_d1 g00_d11 g00_d12 g00_d13 g00_d2 g00_d22 g00_d23 g00_d3 g01 g01_d1 g01_d11 g01_d12 g01_d13 g01_d2 g01_d22 g01_d23 g01_d3 g10 g10_d1 g10_d11 g10_d12 g10_d13 g10_d2 g10_d22 g10_d23 g10_d3 g11 g11_d1 g11_d11 g11_d12 g11_d13 g11_d2 g11_d22 g11_d23 g11_d3 t y0 y1 a0 a1 b bu th thu v0 v1
      = Gen.adj_f_i_general_22_en_out_0_0 f0 f0_d1 f0_d2 f0_d3 f1 f1_d1 f1_d2 f1_d3 g00 g00_d1 g00_d11 g00_d12 g00_d13 g00_d2 g00_d22 g00_d23 g00_d3 g01 g01_d1 g01_d11 g01_d12 g01_d13 g01_d2 g01_d22 g01_d23 g01_d3 g10 g10_d1 g10_d11 g10_d12 g10_d13 g10_d2 g10_d22 g10_d23 g10_d3 g11 g11_d1 g11_d11 g11_d12 g11_d13 g11_d2 g11_d22 g11_d23 g11_d3 t y0 y1 a0 a1 b bu th thu ∧
    Gen.adj_fgp_i_general_22_en_f_0_1 f0 f0_d1 f0_d2 f0_d3 f1 f1_d1 f1_d2 f1_d3 g00 g00_d1 g00_d11 g00_d12 g00_d13 g00_d2 g00_d22 g00_d23 g00_d3 g01 g01_d1 g01_d11 g01_d12 g01_d13 g01_d2 g01_d22 g01_d23 g01_d3 g10 g10_d1 g10_d11 g10_d12 g10_d13 g10_d2 g10_d22 g10_d23 g10_d3 g11 g11_d1 g11_d11 g11_d12 g11_d13 g11_d2 g11_d22 g11_d23 g11_d3 t y0 y1 a0 a1 b bu th thu v0 v1
      = Gen.adj_f_i_general_22_en_out_0_1 f0 f0_d1 f0_d2 f0_d3 f1 f1_d1 f1_d2 f1_d3 g00 g00_d1 g00_d11 g00_d12 g00_d13 g00_d2 g00_d22 g00_d23 g00_d3 g01 g01_d1 g01_d11 g01_d12 g01_d13 g01_d2 g01_d22 g01_d23 g01_d3 g10 g10_d1 g10_d11 g10_d12 g10_d13 g10_d2 g10_d22 g10_d23 g10_d3 g11 g11_d1 g11_d11 g11_d12 g11_d13 g11_d2 g11_d22 g11_d23 g11_d3 t y0 y1 a0 a1 b bu th thu ∧
    Gen.adj_fgp_i_general_22_en_f_0_2 f0 f0_d1 f0_d2 f0_d3 f1 f1_d1 f1_d2 f1_d3 g00 g00_d1 g00_d11 g00_d12 g00_d13 g00_d2 g00_d22 g00_d23 g00_d3 g01 g01_d1 g01_d11 g01_d12 g01_d13 g01_d2 g01_d22 g01_d23 g01_d3 g10 g10_d1 g10_d11 g10_d12 g10_d13 g10_d2 g10_d22 g10_d23 g10_d3 g11 g11_d1 g11_d11 g11_d12 g11_d13 g11_d2 g11_d22 g11_d23 g11_d3 t y0 y1 a0 a1 b bu th thu v0 v1
      = Gen.adj_f_i_general_22_en_out_0_2 f0 f0_d1 f0_d2 f0_d3 f1 f1_d1 f1_d2 f1_d3 g00 g00_d1 g00_d11 g00_d12 g00_d13 g00_d2 g00_d22 g00_d23 g00_d3 g01 g01_d1 g01_d11 g01_d12 g01_d13 g01_d2 g01_d22 g01_d23 g01_d3 g10 g10_d1 g10_d11 g10_d12 g10_d13 g10_d2 g10_d22 g10_d23 g10_d3 g11 g11_d1 g11_d11 g11_d12 g11_d13 g11_d2 g11_d22 g11_d23 g11_d3 t y0 y1 a0 a1 b bu th thu ∧
    Gen.adj_fgp_i_general_22_en_f_0_3 f0 f0_d1 f0_d2 f0_d3 f1 f1_d1 f1_d2 f1_d3 g00 g00_d1 g00_d11 g00_d12 g00_d13 g00_d2 g00_d22 g00_d23 g00_d3 g01 g01_d1 g01_d11 g01_d12 g01_d13 g01_d2 g01_d22 g01_d23 g01_d3 g10 g10_d1 g10_d11 g10_d12 g10_d13 g10_d2 g10_d22 g10_d23 g10_d3 g11 g11_d1 g11_d11 g11_d12 g11_d13 g11_d2 g11_d22 g11_d23 g11_d3 t y0 y1 a0 a1 b bu th thu v0 v1
      = Gen.adj_f_i_general_22_en_out_0_3 f0 f0_d1 f0_d2 f0_d3 f1 f1_d1 f1_d2 f1_d3 g00 g00_d1 g00_d11 g00_d12 g00_d13 g00_d2 g00_d22 g00_d23 g00_d3 g01 g01_d1 g01_d11 g01_d12 g01_d13 g01_d2 g01_d22 g01_d23 g01_d3 g10 g10_d1 g10_d11 g10_d12 g10_d13 g10_d2 g10_d22 g10_d23 g10_d3 g11 g11_d1 g11_d11 g11_d12 g11_d13 g11_d2 g11_d22 g11_d23 g11_d3 t y0 y1 a0 a1 b bu th thu ∧
    Gen.adj_fgp_i_general_22_en_f_0_4 f0 f0_d1 f0_d2 f0_d3 f1 f1_d1 f1_d2 f1_d3 g00 g00_d1 g00_d11 g00_d12 g00_d13 g00_d2 g00_d22 g00_d23 g00_d3 g01 g01_d1 g01_d11 g01_d12 g01_d13 g01_d2 g01_d22 g01_d23 g01_d3 g10 g10_d1 g10_d11 g10_d12 g10_d13 g10_d2 g10_d22 g10_d23 g10_d3 g11 g11_d1 g11_d11 g11_d12 g11_d13 g11_d2 g11_d22 g11_d23 g11_d3 t y0 y1 a0 a1 b bu th thu v0 v1
      = Gen.adj_f_i_general_22_en_out_0_4 f0 f0_d1 f0_d2 f0_d3 f1 f1_d1 f1_d2 f1_d3 g00 g00_d1 g00_d11 g00_d12 g00_d13 g00_d2 g00_d22 g00_d23 g00_d3 g01 g01_d1 g01_d11 g01_d12 g01_d13 g01_d2 g01_d22 g01_d23 g01_d3 g10 g10_d1 g10_d11 g10_d12 g10_d13 g10_d2 g10_d22 g10_d23 g10_d3 g11 g11_d1 g11_d11 g11_d12 g11_d13 g11_d2 g11_d22 g11_d23 g11_d3 t y0 y1 a0 a1 b bu th thu ∧
    Gen.adj_fgp_i_general_22_en_f_0_5 f0 f0_d1 f0_d2 f0_d3 f1 f1_d1 f1_d2 f1_d3 g00 g00_d1 g00_d11 g00_d12 g00_d13 g00_d2 g00_d22 g00_d23 g00_d3 g01 g01_d1 g01_d11 g01_d12 g01_d13 g01_d2 g01_d22 g01_d23 g01_d3 g10 g10_d1 g10_d11 g10_d12 g10_d13 g10_d2 g10_d22 g10_d23 g10_d3 g11 g11_d1 g11_d11 g11_d12 g11_d13 g11_d2 g11_d22 g11_d23 g11_d3 t y0 y1 a0 a1 b bu th thu v0 v1
      = Gen.adj_f_i_general_22_en_out_0_5 f0 f0_d1 f0_d2 f0_d3 f1 f1_d1 f1_d2 f1_d3 g00 g00_d1 g00_d11 g00_d12 g00_d13 g00_d2 g00_d22 g00_d23 g00_d3 g01 g01_d1 g01_d11 g01_d12 g01_d13 g01_d2 g01_d22 g01_d23 g01_d3 g10 g10_d1 g10_d11 g10_d12 g10_d13 g10_d2 g10_d22 g10_d23 g10_d3 g11 g11_d1 g11_d11 g11_d12 g11_d13 g11_d2 g11_d22 g11_d23 g11_d3 t y0 y1 a0 a1 b bu th thu ∧
    Gen.adj_fgp_i_general_22_en_gp_0_0 f0 f0_d1 f0_d2 f0_d3 f1 f1_d1 f1_d2 f1_d3 g00 g00_d1 g00_d11 g00_d12 g00_d13 g00_d2 g00_d22 g00_d23 g00_d3 g01 g01_d1 g01_d11 g01_d12 g01_d13 g01_d2 g01_d22 g01_d23 g01_d3 g10 g10_d1 g10_d11 g10_d12 g10_d13 g10_d2 g10_d22 g10_d23 g10_d3 g11 g11_d1 g11_d11 g11_d12 g11_d13 g11_d2 g11_d22 g11_d23 g11_d3 t y0 y1 a0 a1 b bu th thu v0 v1
      = Gen.adj_gp_i_general_22_en_out_0_0 g00 g00_d1 g00_d2 g00_d3 g01 g01_d1 g01_d2 g01_d3 g10 g10_d1 g10_d2 g10_d3 g11 g11_d1 g11_d2 g11_d3 t y0 y1 a0 a1 b bu th thu v0 v1 ∧
    Gen.adj_fgp_i_general_22_en_gp_0_1 f0 f0_d1 f0_d2 f0_d3 f1 f1_d1 f1_d2 f1_d3 g00 g00_d1 g00_d11 g00_d12 g00_d13 g00_d2 g00_d22 g00_d23 g00_d3 g01 g01_d1 g01_d11 g01_d12 g01_d13 g01_d2 g01_d22 g01_d23 g01_d3 g10 g10_d1 g10_d11 g10_d12 g10_d13 g10_d2 g10_d22 g10_d23 g10_d3 g11 g11_d1 g11_d11 g11_d12 g11_d13 g11_d2 g11_d22 g11_d23 g11_d3 t y0 y1 a0 a1 b bu th thu v0 v1
      = Gen.adj_gp_i_general_22_en_out_0_1 g00 g00_d1 g00_d2 g00_d3 g01 g01_d1 g01_d2 g01_d3 g10 g10_d1 g10_d2 g10_d3 g11 g11_d1 g11_d2 g11_d3 t y0 y1 a0 a1 b bu th thu v0 v1 ∧
    Gen.adj_fgp_i_general_22_en_gp_0_2 f0 f0_d1 f0_d2 f0_d3 f1 f1_d1 f1_d2 f1_d3 g00 g00_d1 g00_d11 g00_d12 g00_d13 g00_d2 g00_d22 g00_d23 g00_d3 g01 g01_d1 g01_d11 g01_d12 g01_d13 g01_d2 g01_d22 g01_d23 g01_d3 g10 g10_d1 g10_d11 g10_d12 g10_d13 g10_d2 g10_d22 g10_d23 g10_d3 g11 g11_d1 g11_d11 g11_d12 g11_d13 g11_d2 g11_d22 g11_d23 g11_d3 t y0 y1 a0 a1 b bu th thu v0 v1
      = Gen.adj_gp_i_general_22_en_out_0_2 g00 g00_d1 g00_d2 g00_d3 g01 g01_d1 g01_d2 g01_d3 g10 g10_d1 g10_d2 g10_d3 g11 g11_d1 g11_d2 g11_d3 t y0 y1 a0 a1 b bu th thu v0 v1 ∧
    Gen.adj_fgp_i_general_22_en_gp_0_3 f0 f0_d1 f0_d2 f0_d3 f1 f1_d1 f1_d2 f1_d3 g00 g00_d1 g00_d11 g00_d12 g00_d13 g00_d2 g00_d22 g00_d23 g00_d3 g01 g01_d1 g01_d11 g01_d12 g01_d13 g01_d2 g01_d22 g01_d23 g01_d3 g10 g10_d1 g10_d11 g10_d12 g10_d13 g10_d2 g10_d22 g10_d23 g10_d3 g11 g11_d1 g11_d11 g11_d12 g11_d13 g11_d2 g11_d22 g11_d23 g11_d3 t y0 y1 a0 a1 b bu th thu v0 v1
      = Gen.adj_gp_i_general_22_en_out_0_3 g00 g00_d1 g00_d2 g00_d3 g01 g01_d1 g01_d2 g01_d3 g10 g10_d1 g10_d2 g10_d3 g11 g11_d1 g11_d2 g11_d3 t y0 y1 a0 a1 b bu th thu v0 v1 ∧
    Gen.adj_fgp_i_general_22_en_gp_0_4 f0 f0_d1 f0_d2 f0_d3 f1 f1_d1 f1_d2 f1_d3 g00 g00_d1 g00_d11 g00_d12 g00_d13 g00_d2 g00_d22 g00_d23 g00_d3 g01 g01_d1 g01_d11 g01_d12 g01_d13 g01_d2 g01_d22 g01_d23 g01_d3 g10 g10_d1 g10_d11 g10_d12 g10_d13 g10_d2 g10_d22 g10_d23 g10_d3 g11 g11_d1 g11_d11 g11_d12 g11_d13 g11_d2 g11_d22 g11_d23 g11_d3 t y0 y1 a0 a1 b bu th thu v0 v1
      = Gen.adj_gp_i_general_22_en_out_0_4 g00 g00_d1 g00_d2 g00_d3 g01 g01_d1 g01_d2 g01_d3 g10 g10_d1 g10_d2 g10_d3 g11 g11_d1 g11_d2 g11_d3 t y0 y1 a0 a1 b bu th thu v0 v1 ∧
    Gen.adj_fgp_i_general_22_en_gp_0_5 f0 f0_d1 f0_d2 f0_d3 f1 f1_d1 f1_d2 f1_d3 g00 g00_d1 g00_d11 g00_d12 g00_d13 g00_d2 g00_d22 g00_d23 g00_d3 g01 g01_d1 g01_d11 g01_d12 g01_d13 g01_d2 g01_d22 g01_d23 g01_d3 g10 g10_d1 g10_d11 g10_d12 g10_d13 g10_d2 g10_d22 g10_d23 g10_d3 g11 g11_d1 g11_d11 g11_d12 g11_d13 g11_d2 g11_d22 g11_d23 g11_d3 t y0 y1 a0 a1 b bu th thu v0 v1
      = Gen.adj_gp_i_general_22_en_out_0_5 g00 g00_d1 g00_d2 g00_d3 g01 g01_d1 g01_d2 g01_d3 g10 g10_d1 g10_d2 g10_d3 g11 g11_d1 g11_d2 g11_d3 t y0 y1 a0 a1 b bu th thu v0 v1 := by
  refine ⟨?_, ?_, ?_, ?_, ?_, ?_, ?_, ?_, ?_, ?_, ?_, ?_⟩ <;> simp only [Gen.adj_fgp_i_general_22_en_f_0_0, Gen.adj_f_i_general_22_en_out_0_0, Gen.adj_fgp_i_general_22_en_f_0_1, Gen.adj_f_i_general_22_en_out_0_1, Gen.adj_fgp_i_general_22_en_f_0_2, Gen.adj_f_i_general_22_en_out_0_2, Gen.adj_fgp_i_general_22_en_f_0_3, Gen.adj_f_i_general_22_en_out_0_3, Gen.adj_fgp_i_general_22_en_f_0_4, Gen.adj_f_i_general_22_en_out_0_4, Gen.adj_fgp_i_general_22_en_f_0_5, Gen.adj_f_i_general_22_en_out_0_5, Gen.adj_fgp_i_general_22_en_gp_0_0, Gen.adj_gp_i_general_22_en_out_0_0, Gen.adj_fgp_i_general_22_en_gp_0_1, Gen.adj_gp_i_general_22_en_out_0_1, Gen.adj_fgp_i_general_22_en_gp_0_2, Gen.adj_gp_i_general_22_en_out_0_2, Gen.adj_fgp_i_general_22_en_gp_0_3, Gen.adj_gp_i_general_22_en_out_0_3, Gen.adj_fgp_i_general_22_en_gp_0_4, Gen.adj_gp_i_general_22_en_out_0_4, Gen.adj_fgp_i_general_22_en_gp_0_5, Gen.adj_gp_i_general_22_en_out_0_5] <;> ring

theorem adj_fgp_i_general_22_en_graph (f0 : K → K → K → K → K) (f0_d1 : K → K → K → K → K) (f0_d2 : K → K → K → K → K) (f0_d3 : K → K → K → K → K) (f1 : K → K → K → K → K) (f1_d1 : K → K → K → K → K) (f1_d2 : K → K → K → K → K) (f1_d3 : K → K → K → K → K) (g00 : K → K → K → K → K) (g00_d1 : K → K → K → K → K) (g00_d11 : K → K → K → K → K) (g00_d12 : K → K → K → K → K) (g00_d13 : K → K → K → K → K) (g00_d2 : K → K → K → K → K) (g00_d22 : K → K → K → K → K) (g00_d23 : K → K → K → K → K) (g00_d3 : K → K → K → K → K) (g01 : K → K → K → K → K) (g01_d1 : K → K → K → K → K) (g01_d11 : K → K → K → K → K) (g01_d12 : K → K → K → K → K) (g01_d13 : K → K → K → K → K) (g01_d2 : K → K → K → K → K) (g01_d22 : K → K → K → K → K) (g01_d23 : K → K → K → K → K) (g01_d3 : K → K → K → K → K) (g10 : K → K → K → K → K) (g10_d1 : K → K → K → K → K) (g10_d11 : K → K → K → K → K) (g10_d12 : K → K → K → K → K) (g10_d13 : K → K → K → K → K) (g10_d2 : K → K → K → K → K) (g10_d22 : K → K → K → K → K) (g10_d23 : K → K → K → K → K) (g10_d3 : K → K → K → K → K) (g11 : K → K → K → K → K) (g11_d1 : K → K → K → K → K) (g11_d11 : K → K → K → K → K) (g11_d12 : K → K → K → K → K) (g11_d13 : K → K → K → K → K) (g11_d2 : K → K → K → K → K) (g11_d22 : K → K → K → K → K) (g11_d23 : K → K → K → K → K) (g11_d3 : K → K → K → K → K) (t y0 y1 a0 a1 b bu th thu v0 v1 : K) :
    Gen.adj_fgp_i_general_22_en_rg_f f0 f0_d1 f0_d2 f0_d3 f1 f1_d1 f1_d2 f1_d3 g00 g00_d1 g00_d11 g00_d12 g00_d13 g00_d2 g00_d22 g00_d23 g00_d3 g01 g01_d1 g01_d11 g01_d12 g01_d13 g01_d2 g01_d22 g01_d23 g01_d3 g10 g10_d1 g10_d11 g10_d12 g10_d13 g10_d2 g10_d22 g10_d23 g10_d3 g11 g11_d1 g11_d11 g11_d12 g11_d13 g11_d2 g11_d22 g11_d23 g11_d3 t y0 y1 a0 a1 b bu th thu v0 v1 = 1 ∧
    Gen.adj_fgp_i_general_22_en_leaf_f f0 f0_d1 f0_d2 f0_d3 f1 f1_d1 f1_d2 f1_d3 g00 g00_d1 g00_d11 g00_d12 g00_d13 g00_d2 g00_d22 g00_d23 g00_d3 g01 g01_d1 g01_d11 g01_d12 g01_d13 g01_d2 g01_d22 g01_d23 g01_d3 g10 g10_d1 g10_d11 g10_d12 g10_d13 g10_d2 g10_d22 g10_d23 g10_d3 g11 g11_d1 g11_d11 g11_d12 g11_d13 g11_d2 g11_d22 g11_d23 g11_d3 t y0 y1 a0 a1 b bu th thu v0 v1 = 0 ∧
    Gen.adj_fgp_i_general_22_en_rg_gp f0 f0_d1 f0_d2 f0_d3 f1 f1_d1 f1_d2 f1_d3 g00 g00_d1 g00_d11 g00_d12 g00_d13 g00_d2 g00_d22 g00_d23 g00_d3 g01 g01_d1 g01_d11 g01_d12 g01_d13 g01_d2 g01_d22 g01_d23 g01_d3 g10 g10_d1 g10_d11 g10_d12 g10_d13 g10_d2 g10_d22 g10_d23 g10_d3 g11 g11_d1 g11_d11 g11_d12 g11_d13 g11_d2 g11_d22 g11_d23 g11_d3 t y0 y1 a0 a1 b bu th thu v0 v1 = 1 ∧
    Gen.adj_fgp_i_general_22_en_leaf_gp f0 f0_d1 f0_d2 f0_d3 f1 f1_d1 f1_d2 f1_d3 g00 g00_d1 g00_d11 g00_d12 g00_d13 g00_d2 g00_d22 g00_d23 g00_d3 g01 g01_d1 g01_d11 g01_d12 g01_d13 g01_d2 g01_d22 g01_d23 g01_d3 g10 g10_d1 g10_d11 g10_d12 g10_d13 g10_d2 g10_d22 g10_d23 g10_d3 g11 g11_d1 g11_d11 g11_d12 g11_d13 g11_d2 g11_d22 g11_d23 g11_d3 t y0 y1 a0 a1 b bu th thu v0 v1 = 0 ∧
    Gen.adj_fgp_i_general_22_en_rg_z_after f0 f0_d1 f0_d2 f0_d3 f1 f1_d1 f1_d2 f1_d3 g00 g00_d1 g00_d11 g00_d12 g00_d13 g00_d2 g00_d22 g00_d23 g00_d3 g01 g01_d1 g01_d11 g01_d12 g01_d13 g01_d2 g01_d22 g01_d23 g01_d3 g10 g10_d1 g10_d11 g10_d12 g10_d13 g10_d2 g10_d22 g10_d23 g10_d3 g11 g11_d1 g11_d11 g11_d12 g11_d13 g11_d2 g11_d22 g11_d23 g11_d3 t y0 y1 a0 a1 b bu th thu v0 v1 = 1 ∧
    Gen.adj_fgp_i_general_22_en_leaf_z_after f0 f0_d1 f0_d2 f0_d3 f1 f1_d1 f1_d2 f1_d3 g00 g00_d1 g00_d11 g00_d12 g00_d13 g00_d2 g00_d22 g00_d23 g00_d3 g01 g01_d1 g01_d11 g01_d12 g01_d13 g01_d2 g01_d22 g01_d23 g01_d3 g10 g10_d1 g10_d11 g10_d12 g10_d13 g10_d2 g10_d22 g10_d23 g10_d3 g11 g11_d1 g11_d11 g11_d12 g11_d13 g11_d2 g11_d22 g11_d23 g11_d3 t y0 y1 a0 a1 b bu th thu v0 v1 = 1 := by
  refine ⟨?_, ?_, ?_, ?_, ?_, ?_⟩ <;> simp only [Gen.adj_fgp_i_general_22_en_rg_f, Gen.adj_fgp_i_general_22_en_leaf_f, Gen.adj_fgp_i_general_22_en_rg_gp, Gen.adj_fgp_i_general_22_en_leaf_gp, Gen.adj_fgp_i_general_22_en_rg_z_after, Gen.adj_fgp_i_general_22_en_leaf_z_after]

theorem adj_f_s_diagonal_11_ng_spec (f : K → K → K → K) (f_d1 : K → K → K → K) (f_d2 : K → K → K → K) (g : K → K → K → K) (g_d1 : K → K → K → K) (g_d11 : K → K → K → K) (g_d12 : K → K → K → K) (g_d2 : K → K → K → K) (t y0 a0 b bu th thu : K) :
    Gen.adj_f_s_diagonal_11_ng_out_0_0 f f_d1 f_d2 t y0 a0 b bu th thu
      = stratDriftY (jet_diagonal_11 f f_d1 f_d2 g g_d1 g_d11 g_d12 g_d2 t y0 th) 0 ∧
    Gen.adj_f_s_diagonal_11_ng_out_0_1 f f_d1 f_d2 t y0 a0 b bu th thu
      = stratDriftA (jet_diagonal_11 f f_d1 f_d2 g g_d1 g_d11 g_d12 g_d2 t y0 th) ![a0] 0 ∧
    Gen.adj_f_s_diagonal_11_ng_out_0_2 f f_d1 f_d2 t y0 a0 b bu th thu
      = stratDriftTh (jet_diagonal_11 f f_d1 f_d2 g g_d1 g_d11 g_d12 g_d2 t y0 th) ![a0] 0 ∧
    Gen.adj_f_s_diagonal_11_ng_out_0_3 f f_d1 f_d2 t y0 a0 b bu th thu
      = stratDriftTh (jet_diagonal_11 f f_d1 f_d2 g g_d1 g_d11 g_d12 g_d2 t y0 th) ![a0] 1 := by
  refine ⟨?_, ?_, ?_, ?_⟩ <;>
  simp [Gen.adj_f_s_diagonal_11_ng_out_0_0, Gen.adj_f_s_diagonal_11_ng_out_0_1, Gen.adj_f_s_diagonal_11_ng_out_0_2, Gen.adj_f_s_diagonal_11_ng_out_0_3, jet_diagonal_11, stratDriftY, stratDriftA, stratDriftTh, itoDriftY, itoDriftA, itoDriftTh, gProdY, gProdA, gProdTh, gdgY, gdgA, gdgTh, driftY, driftA, driftTh, diffY, diffA, diffTh, itoCorr, itoCorrY, itoCorrTh, fStrat, fStratY, fStratTh, colCorrY, colCorrA, colCorrTh, Fin.sum_univ_two, Fin.sum_univ_one, Fin.isValue, Matrix.cons_val_zero, Matrix.cons_val_one, Matrix.cons_val_fin_one, Matrix.head_cons] <;> ring

theorem adj_f_s_diagonal_11_ng_unused_param_zero (f : K → K → K → K) (f_d1 : K → K → K → K) (f_d2 : K → K → K → K) (g : K → K → K → K) (g_d1 : K → K → K → K) (g_d11 : K → K → K → K) (g_d12 : K → K → K → K) (g_d2 : K → K → K → K) (t y0 a0 b bu th thu : K) :
    Gen.adj_f_s_diagonal_11_ng_out_0_3 f f_d1 f_d2 t y0 a0 b bu th thu = 0 := by
  simp [Gen.adj_f_s_diagonal_11_ng_out_0_3]

theorem adj_f_s_diagonal_11_ng_graph (f : K → K → K → K) (f_d1 : K → K → K → K) (f_d2 : K → K → K → K) (g : K → K → K → K) (g_d1 : K → K → K → K) (g_d11 : K → K → K → K) (g_d12 : K → K → K → K) (g_d2 : K → K → K → K) (t y0 a0 b bu th thu : K) :
    Gen.adj_f_s_diagonal_11_ng_rg_out f f_d1 f_d2 t y0 a0 b bu th thu = 0 ∧
    Gen.adj_f_s_diagonal_11_ng_leaf_out f f_d1 f_d2 t y0 a0 b bu th thu = 1 ∧
    Gen.adj_f_s_diagonal_11_ng_rg_z_after f f_d1 f_d2 t y0 a0 b bu th thu = 0 ∧
    Gen.adj_f_s_diagonal_11_ng_leaf_z_after f f_d1 f_d2 t y0 a0 b bu th thu = 1 := by
  refine ⟨?_, ?_, ?_, ?_⟩ <;> simp only [Gen.adj_f_s_diagonal_11_ng_rg_out, Gen.adj_f_s_diagonal_11_ng_leaf_out, Gen.adj_f_s_diagonal_11_ng_rg_z_after, Gen.adj_f_s_diagonal_11_ng_leaf_z_after]

theorem adj_f_s_diagonal_11_en_spec (f : K → K → K → K) (f_d1 : K → K → K → K) (f_d11 : K → K → K → K) (f_d12 : K → K → K → K) (f_d2 : K → K → K → K) (f_d22 : K → K → K → K) (g : K → K → K → K) (g_d1 : K → K → K → K) (g_d11 : K → K → K → K) (g_d12 : K → K → K → K) (g_d2 : K → K → K → K) (t y0 a0 b bu th thu : K) :
    Gen.adj_f_s_diagonal_11_en_out_0_0 f f_d1 f_d11 f_d12 f_d2 f_d22 t y0 a0 b bu th thu
      = stratDriftY (jet_diagonal_11 f f_d1 f_d2 g g_d1 g_d11 g_d12 g_d2 t y0 th) 0 ∧
    Gen.adj_f_s_diagonal_11_en_out_0_1 f f_d1 f_d11 f_d12 f_d2 f_d22 t y0 a0 b bu th thu
      = stratDriftA (jet_diagonal_11 f f_d1 f_d2 g g_d1 g_d11 g_d12 g_d2 t y0 th) ![a0] 0 ∧
    Gen.adj_f_s_diagonal_11_en_out_0_2 f f_d1 f_d11 f_d12 f_d2 f_d22 t y0 a0 b bu th thu
      = stratDriftTh (jet_diagonal_11 f f_d1 f_d2 g g_d1 g_d11 g_d12 g_d2 t y0 th) ![a0] 0 ∧
    Gen.adj_f_s_diagonal_11_en_out_0_3 f f_d1 f_d11 f_d12 f_d2 f_d22 t y0 a0 b bu th thu
      = stratDriftTh (jet_diagonal_11 f f_d1 f_d2 g g_d1 g_d11 g_d12 g_d2 t y0 th) ![a0] 1 := by
  refine ⟨?_, ?_, ?_, ?_⟩ <;>
  simp [Gen.adj_f_s_diagonal_11_en_out_0_0, Gen.adj_f_s_diagonal_11_en_out_0_1, Gen.adj_f_s_diagonal_11_en_out_0_2, Gen.adj_f_s_diagonal_11_en_out_0_3, jet_diagonal_11, stratDriftY, stratDriftA, stratDriftTh, itoDriftY, itoDriftA, itoDriftTh, gProdY, gProdA, gProdTh, gdgY, gdgA, gdgTh, driftY, driftA, driftTh, diffY, diffA, diffTh, itoCorr, itoCorrY, itoCorrTh, fStrat, fStratY, fStratTh, colCorrY, colCorrA, colCorrTh, Fin.sum_univ_two, Fin.sum_univ_one, Fin.isValue, Matrix.cons_val_zero, Matrix.cons_val_one, Matrix.cons_val_fin_one, Matrix.head_cons] <;> ring

theorem adj_f_s_diagonal_11_en_unused_param_zero (f : K → K → K → K) (f_d1 : K → K → K → K) (f_d11 : K → K → K → K) (f_d12 : K → K → K → K) (f_d2 : K → K → K → K) (f_d22 : K → K → K → K) (g : K → K → K → K) (g_d1 : K → K → K → K) (g_d11 : K → K → K → K) (g_d12 : K → K → K → K) (g_d2 : K → K → K → K) (t y0 a0 b bu th thu : K) :
    Gen.adj_f_s_diagonal_11_en_out_0_3 f f_d1 f_d11 f_d12 f_d2 f_d22 t y0 a0 b bu th thu = 0 := by
  simp [Gen.adj_f_s_diagonal_11_en_out_0_3]

theorem adj_f_s_diagonal_11_en_graph (f : K → K → K → K) (f_d1 : K → K → K → K) (f_d11 : K → K → K → K) (f_d12 : K → K → K → K) (f_d2 : K → K → K → K) (f_d22 : K → K → K → K) (g : K → K → K → K) (g_d1 : K → K → K → K) (g_d11 : K → K → K → K) (g_d12 : K → K → K → K) (g_d2 : K → K → K → K) (t y0 a0 b bu th thu : K) :
    Gen.adj_f_s_diagonal_11_en_rg_out f f_d1 f_d11 f_d12 f_d2 f_d22 t y0 a0 b bu th thu = 1 ∧
    Gen.adj_f_s_diagonal_11_en_leaf_out f f_d1 f_d11 f_d12 f_d2 f_d22 t y0 a0 b bu th thu = 0 ∧
    Gen.adj_f_s_diagonal_11_en_rg_z_after f f_d1 f_d11 f_d12 f_d2 f_d22 t y0 a0 b bu th thu = 1 ∧
    Gen.adj_f_s_diagonal_11_en_leaf_z_after f f_d1 f_d11 f_d12 f_d2 f_d22 t y0 a0 b bu th thu = 1 := by
  refine ⟨?_, ?_, ?_, ?_⟩ <;> simp only [Gen.adj_f_s_diagonal_11_en_rg_out, Gen.adj_f_s_diagonal_11_en_leaf_out, Gen.adj_f_s_diagonal_11_en_rg_z_after, Gen.adj_f_s_diagonal_11_en_leaf_z_after]

theorem adj_gp_s_diagonal_11_ng_spec (f : K → K → K → K) (f_d1 : K → K → K → K) (f_d2 : K → K → K → K) (g : K → K → K → K) (g_d1 : K → K → K → K) (g_d11 : K → K → K → K) (g_d12 : K → K → K → K) (g_d2 : K → K → K → K) (t y0 a0 b bu th thu v0 : K) :
    Gen.adj_gp_s_diagonal_11_ng_out_0_0 g g_d1 g_d2 t y0 a0 b bu th thu v0
      = gProdY (jet_diagonal_11 f f_d1 f_d2 g g_d1 g_d11 g_d12 g_d2 t y0 th) ![v0] 0 ∧
    Gen.adj_gp_s_diagonal_11_ng_out_0_1 g g_d1 g_d2 t y0 a0 b bu th thu v0
      = gProdA (jet_diagonal_11 f f_d1 f_d2 g g_d1 g_d11 g_d12 g_d2 t y0 th) ![a0] ![v0] 0 ∧
    Gen.adj_gp_s_diagonal_11_ng_out_0_2 g g_d1 g_d2 t y0 a0 b bu th thu v0
      = gProdTh (jet_diagonal_11 f f_d1 f_d2 g g_d1 g_d11 g_d12 g_d2 t y0 th) ![a0] ![v0] 0 ∧
    Gen.adj_gp_s_diagonal_11_ng_out_0_3 g g_d1 g_d2 t y0 a0 b bu th thu v0
      = gProdTh (jet_diagonal_11 f f_d1 f_d2 g g_d1 g_d11 g_d12 g_d2 t y0 th) ![a0] ![v0] 1 := by
  refine ⟨?_, ?_, ?_, ?_⟩ <;>
  simp [Gen.adj_gp_s_diagonal_11_ng_out_0_0, Gen.adj_gp_s_diagonal_11_ng_out_0_1, Gen.adj_gp_s_diagonal_11_ng_out_0_2, Gen.adj_gp_s_diagonal_11_ng_out_0_3, jet_diagonal_11, stratDriftY, stratDriftA, stratDriftTh, itoDriftY, itoDriftA, itoDriftTh, gProdY, gProdA, gProdTh, gdgY, gdgA, gdgTh, driftY, driftA, driftTh, diffY, diffA, diffTh, itoCorr, itoCorrY, itoCorrTh, fStrat, fStratY, fStratTh, colCorrY, colCorrA, colCorrTh, Fin.sum_univ_two, Fin.sum_univ_one, Fin.isValue, Matrix.cons_val_zero, Matrix.cons_val_one, Matrix.cons_val_fin_one, Matrix.head_cons] <;> ring

theorem adj_gp_s_diagonal_11_ng_unused_param_zero (f : K → K → K → K) (f_d1 : K → K → K → K) (f_d2 : K → K → K → K) (g : K → K → K → K) (g_d1 : K → K → K → K) (g_d11 : K → K → K → K) (g_d12 : K → K → K → K) (g_d2 : K → K → K → K) (t y0 a0 b bu th thu v0 : K) :
    Gen.adj_gp_s_diagonal_11_ng_out_0_3 g g_d1 g_d2 t y0 a0 b bu th thu v0 = 0 := by
  simp [Gen.adj_gp_s_diagonal_11_ng_out_0_3]

theorem adj_gp_s_diagonal_11_ng_graph (f : K → K → K → K) (f_d1 : K → K → K → K) (f_d2 : K → K → K → K) (g : K → K → K → K) (g_d1 : K → K → K → K) (g_d11 : K → K → K → K) (g_d12 : K → K → K → K) (g_d2 : K → K → K → K) (t y0 a0 b bu th thu v0 : K) :
    Gen.adj_gp_s_diagonal_11_ng_rg_out g g_d1 g_d2 t y0 a0 b bu th thu v0 = 0 ∧
    Gen.adj_gp_s_diagonal_11_ng_leaf_out g g_d1 g_d2 t y0 a0 b bu th thu v0 = 1 ∧
    Gen.adj_gp_s_diagonal_11_ng_rg_z_after g g_d1 g_d2 t y0 a0 b bu th thu v0 = 0 ∧
    Gen.adj_gp_s_diagonal_11_ng_leaf_z_after g g_d1 g_d2 t y0 a0 b bu th thu v0 = 1 := by
  refine ⟨?_, ?_, ?_, ?_⟩ <;> simp only [Gen.adj_gp_s_diagonal_11_ng_rg_out, Gen.adj_gp_s_diagonal_11_ng_leaf_out, Gen.adj_gp_s_diagonal_11_ng_rg_z_after, Gen.adj_gp_s_diagonal_11_ng_leaf_z_after]

theorem adj_gp_s_diagonal_11_en_spec (f : K → K → K → K) (f_d1 : K → K → K → K) (f_d2 : K → K → K → K) (g : K → K → K → K) (g_d1 : K → K → K → K) (g_d11 : K → K → K → K) (g_d12 : K → K → K → K) (g_d2 : K → K → K → K) (g_d22 : K → K → K → K) (t y0 a0 b bu th thu v0 : K) :
    Gen.adj_gp_s_diagonal_11_en_out_0_0 g g_d1 g_d11 g_d12 g_d2 g_d22 t y0 a0 b bu th thu v0
      = gProdY (jet_diagonal_11 f f_d1 f_d2 g g_d1 g_d11 g_d12 g_d2 t y0 th) ![v0] 0 ∧
    Gen.adj_gp_s_diagonal_11_en_out_0_1 g g_d1 g_d11 g_d12 g_d2 g_d22 t y0 a0 b bu th thu v0
      = gProdA (jet_diagonal_11 f f_d1 f_d2 g g_d1 g_d11 g_d12 g_d2 t y0 th) ![a0] ![v0] 0 ∧
    Gen.adj_gp_s_diagonal_11_en_out_0_2 g g_d1 g_d11 g_d12 g_d2 g_d22 t y0 a0 b bu th thu v0
      = gProdTh (jet_diagonal_11 f f_d1 f_d2 g g_d1 g_d11 g_d12 g_d2 t y0 th) ![a0] ![v0] 0 ∧
    Gen.adj_gp_s_diagonal_11_en_out_0_3 g g_d1 g_d11 g_d12 g_d2 g_d22 t y0 a0 b bu th thu v0
      = gProdTh (jet_diagonal_11 f f_d1 f_d2 g g_d1 g_d11 g_d12 g_d2 t y0 th) ![a0] ![v0] 1 := by
  refine ⟨?_, ?_, ?_, ?_⟩ <;>
  simp [Gen.adj_gp_s_diagonal_11_en_out_0_0, Gen.adj_gp_s_diagonal_11_en_out_0_1, Gen.adj_gp_s_diagonal_11_en_out_0_2, Gen.adj_gp_s_diagonal_11_en_out_0_3, jet_diagonal_11, stratDriftY, stratDriftA, stratDriftTh, itoDriftY, itoDriftA, itoDriftTh, gProdY, gProdA, gProdTh, gdgY, gdgA, gdgTh, driftY, driftA, driftTh, diffY, diffA, diffTh, itoCorr, itoCorrY, itoCorrTh, fStrat, fStratY, fStratTh, colCorrY, colCorrA, colCorrTh, Fin.sum_univ_two, Fin.sum_univ_one, Fin.isValue, Matrix.cons_val_zero, Matrix.cons_val_one, Matrix.cons_val_fin_one, Matrix.head_cons] <;> ring

theorem adj_gp_s_diagonal_11_en_unused_param_zero (f : K → K → K → K) (f_d1 : K → K → K → K) (f_d2 : K → K → K → K) (g : K → K → K → K) (g_d1 : K → K → K → K) (g_d11 : K → K → K → K) (g_d12 : K → K → K → K) (g_d2 : K → K → K → K) (g_d22 : K → K → K → K) (t y0 a0 b bu th thu v0 : K) :
    Gen.adj_gp_s_diagonal_11_en_out_0_3 g g_d1 g_d11 g_d12 g_d2 g_d22 t y0 a0 b bu th thu v0 = 0 := by
  simp [Gen.adj_gp_s_diagonal_11_en_out_0_3]

theorem adj_gp_s_diagonal_11_en_graph (f : K → K → K → K) (f_d1 : K → K → K → K) (f_d2 : K → K → K → K) (g : K → K → K → K) (g_d1 : K → K → K → K) (g_d11 : K → K → K → K) (g_d12 : K → K → K → K) (g_d2 : K → K → K → K) (g_d22 : K → K → K → K) (t y0 a0 b bu th thu v0 : K) :
    Gen.adj_gp_s_diagonal_11_en_rg_out g g_d1 g_d11 g_d12 g_d2 g_d22 t y0 a0 b bu th thu v0 = 1 ∧
    Gen.adj_gp_s_diagonal_11_en_leaf_out g g_d1 g_d11 g_d12 g_d2 g_d22 t y0 a0 b bu th thu v0 = 0 ∧
    Gen.adj_gp_s_diagonal_11_en_rg_z_after g g_d1 g_d11 g_d12 g_d2 g_d22 t y0 a0 b bu th thu v0 = 1 ∧
    Gen.adj_gp_s_diagonal_11_en_leaf_z_after g g_d1 g_d11 g_d12 g_d2 g_d22 t y0 a0 b bu th thu v0 = 1 := by
  refine ⟨?_, ?_, ?_, ?_⟩ <;> simp only [Gen.adj_gp_s_diagonal_11_en_rg_out, Gen.adj_gp_s_diagonal_11_en_leaf_out, Gen.adj_gp_s_diagonal_11_en_rg_z_after, Gen.adj_gp_s_diagonal_11_en_leaf_z_after]

theorem adj_fgp_s_diagonal_11_ng_unused_param_zero (f : K → K → K → K) (f_d1 : K → K → K → K) (f_d2 : K → K → K → K) (g : K → K → K → K) (g_d1 : K → K → K → K) (g_d11 : K → K → K → K) (g_d12 : K → K → K → K) (g_d2 : K → K → K → K) (t y0 a0 b bu th thu v0 : K) :
    Gen.adj_fgp_s_diagonal_11_ng_f_0_3 f f_d1 f_d2 g g_d1 g_d2 t y0 a0 b bu th thu v0 = 0 ∧
    Gen.adj_fgp_s_diagonal_11_ng_gp_0_3 f f_d1 f_d2 g g_d1 g_d2 t y0 a0 b bu th thu v0 = 0 := by
  refine ⟨?_, ?_⟩ <;> simp [Gen.adj_fgp_s_diagonal_11_ng_f_0_3, Gen.adj_fgp_s_diagonal_11_ng_gp_0_3]

theorem adj_fgp_s_diagonal_11_ng_pair (f : K → K → K → K) (f_d1 : K → K → K → K) (f_d2 : K → K → K → K) (g : K → K → K → K) (g_d1 : K → K → K → K) (g_d11 : K → K → K → K) (g_d12 : K → K → K → K) (g_d2 : K → K → K → K) (t y0 a0 b bu th thu v0 : K) :
    Gen.adj_fgp_s_diagonal_11_ng_f_0_0 f f_d1 f_d2 g g_d1 g_d2 t y0 a0 b bu th thu v0
      = Gen.adj_f_s_diagonal_11_ng_out_0_0 f f_d1 f_d2 t y0 a0 b bu th thu ∧
    Gen.adj_fgp_s_diagonal_11_ng_f_0_1 f f_d1 f_d2 g g_d1 g_d2 t y0 a0 b bu th thu v0
      = Gen.adj_f_s_diagonal_11_ng_out_0_1 f f_d1 f_d2 t y0 a0 b bu th thu ∧
    Gen.adj_fgp_s_diagonal_11_ng_f_0_2 f f_d1 f_d2 g g_d1 g_d2 t y0 a0 b bu th thu v0
      = Gen.adj_f_s_diagonal_11_ng_out_0_2 f f_d1 f_d2 t y0 a0 b bu th thu ∧
    Gen.adj_fgp_s_diagonal_11_ng_f_0_3 f f_d1 f_d2 g g_d1 g_d2 t y0 a0 b bu th thu v0
      = Gen.adj_f_s_diagonal_11_ng_out_0_3 f f_d1 f_d2 t y0 a0 b bu th thu ∧
    Gen.adj_fgp_s_diagonal_11_ng_gp_0_0 f f_d1 f_d2 g g_d1 g_d2 t y0 a0 b bu th thu v0
      = Gen.adj_gp_s_diagonal_11_ng_out_0_0 g g_d1 g_d2 t y0 a0 b bu th thu v0 ∧
    Gen.adj_fgp_s_diagonal_11_ng_gp_0_1 f f_d1 f_d2 g g_d1 g_d2 t y0 a0 b bu th thu v0
      = Gen.adj_gp_s_diagonal_11_ng_out_0_1 g g_d1 g_d2 t y0 a0 b bu th thu v0 ∧
    Gen.adj_fgp_s_diagonal_11_ng_gp_0_2 f f_d1 f_d2 g g_d1 g_d2 t y0 a0 b bu th thu v0
      = Gen.adj_gp_s_diagonal_11_ng_out_0_2 g g_d1 g_d2 t y0 a0 b bu th thu v0 ∧
    Gen.adj_fgp_s_diagonal_11_ng_gp_0_3 f f_d1 f_d2 g g_d1 g_d2 t y0 a0 b bu th thu v0
      = Gen.adj_gp_s_diagonal_11_ng_out_0_3 g g_d1 g_d2 t y0 a0 b bu th thu v0 := by
  refine ⟨?_, ?_, ?_, ?_, ?_, ?_, ?_, ?_⟩ <;> simp only [Gen.adj_fgp_s_diagonal_11_ng_f_0_0, Gen.adj_f_s_diagonal_11_ng_out_0_0, Gen.adj_fgp_s_diagonal_11_ng_f_0_1, Gen.adj_f_s_diagonal_11_ng_out_0_1, Gen.adj_fgp_s_diagonal_11_ng_f_0_2, Gen.adj_f_s_diagonal_11_ng_out_0_2, Gen.adj_fgp_s_diagonal_11_ng_f_0_3, Gen.adj_f_s_diagonal_11_ng_out_0_3, Gen.adj_fgp_s_diagonal_11_ng_gp_0_0, Gen.adj_gp_s_diagonal_11_ng_out_0_0, Gen.adj_fgp_s_diagonal_11_ng_gp_0_1, Gen.adj_gp_s_diagonal_11_ng_out_0_1, Gen.adj_fgp_s_diagonal_11_ng_gp_0_2, Gen.adj_gp_s_diagonal_11_ng_out_0_2, Gen.adj_fgp_s_diagonal_11_ng_gp_0_3, Gen.adj_gp_s_diagonal_11_ng_out_0_3] <;> ring

theorem adj_fgp_s_diagonal_11_ng_graph (f : K → K → K → K) (f_d1 : K → K → K → K) (f_d2 : K → K → K → K) (g : K → K → K → K) (g_d1 : K → K → K → K) (g_d11 : K → K → K → K) (g_d12 : K → K → K → K) (g_d2 : K → K → K → K) (t y0 a0 b bu th thu v0 : K) :
    Gen.adj_fgp_s_diagonal_11_ng_rg_f f f_d1 f_d2 g g_d1 g_d2 t y0 a0 b bu th thu v0 = 0 ∧
    Gen.adj_fgp_s_diagonal_11_ng_leaf_f f f_d1 f_d2 g g_d1 g_d2 t y0 a0 b bu th thu v0 = 1 ∧
    Gen.adj_fgp_s_diagonal_11_ng_rg_gp f f_d1 f_d2 g g_d1 g_d2 t y0 a0 b bu th thu v0 = 0 ∧
    Gen.adj_fgp_s_diagonal_11_ng_leaf_gp f f_d1 f_d2 g g_d1 g_d2 t y0 a0 b bu th thu v0 = 1 ∧
    Gen.adj_fgp_s_diagonal_11_ng_rg_z_after f f_d1 f_d2 g g_d1 g_d2 t y0 a0 b bu th thu v0 = 0 ∧
    Gen.adj_fgp_s_diagonal_11_ng_leaf_z_after f f_d1 f_d2 g g_d1 g_d2 t y0 a0 b bu th thu v0 = 1 := by
  refine ⟨?_, ?_, ?_, ?_, ?_, ?_⟩ <;> simp only [Gen.adj_fgp_s_diagonal_11_ng_rg_f, Gen.adj_fgp_s_diagonal_11_ng_leaf_f, Gen.adj_fgp_s_diagonal_11_ng_rg_gp, Gen.adj_fgp_s_diagonal_11_ng_leaf_gp, Gen.adj_fgp_s_diagonal_11_ng_rg_z_after, Gen.adj_fgp_s_diagonal_11_ng_leaf_z_after]

theorem adj_fgp_s_diagonal_11_en_unused_param_zero (f : K → K → K → K) (f_d1 : K → K → K → K) (f_d2 : K → K → K → K) (g : K → K → K → K) (g_d1 : K → K → K → K) (g_d11 : K → K → K → K) (g_d12 : K → K → K → K) (g_d2 : K → K → K → K) (t y0 a0 b bu th thu v0 : K) :
    Gen.adj_fgp_s_diagonal_11_en_f_0_3 f f_d1 f_d2 g g_d1 g_d2 t y0 a0 b bu th thu v0 = 0 ∧
    Gen.adj_fgp_s_diagonal_11_en_gp_0_3 f f_d1 f_d2 g g_d1 g_d2 t y0 a0 b bu th thu v0 = 0 := by
  refine ⟨?_, ?_⟩ <;> simp [Gen.adj_fgp_s_diagonal_11_en_f_0_3, Gen.adj_fgp_s_diagonal_11_en_gp_0_3]

theorem adj_fgp_s_diagonal_11_en_pair (f : K → K → K → K) (f_d1 : K → K → K → K) (f_d2 : K → K → K → K) (g : K → K → K → K) (g_d1 : K → K → K → K) (g_d11 : K → K → K → K) (g_d12 : K → K → K → K) (g_d2 : K → K → K → K) (t y0 a0 b bu th thu v0 : K) :
    Gen.adj_fgp_s_diagonal_11_en_f_0_0 f f_d1 f_d2 g g_d1 g_d2 t y0 a0 b bu th thu v0
      = Gen.adj_f_s_diagonal_11_en_out_0_0 f f_d1 f_d11 f_d12 f_d2 f_d22 t y0 a0 b bu th thu ∧
    Gen.adj_fgp_s_diagonal_11_en_f_0_1 f f_d1 f_d2 g g_d1 g_d2 t y0 a0 b bu th thu v0
      = Gen.adj_f_s_diagonal_11_en_out_0_1 f f_d1 f_d11 f_d12 f_d2 f_d22 t y0 a0 b bu th thu ∧
    Gen.adj_fgp_s_diagonal_11_en_f_0_2 f f_d1 f_d2 g g_d1 g_d2 t y0 a0 b bu th thu v0
      = Gen.adj_f_s_diagonal_11_en_out_0_2 f f_d1 f_d11 f_d12 f_d2 f_d22 t y0 a0 b bu th thu ∧
    Gen.adj_fgp_s_diagonal_11_en_f_0_3 f f_d1 f_d2 g g_d1 g_d2 t y0 a0 b bu th thu v0
      = Gen.adj_f_s_diagonal_11_en_out_0_3 f f_d1 f_d11 f_d12 f_d2 f_d22 t y0 a0 b bu th thu ∧
    Gen.adj_fgp_s_diagonal_11_en_gp_0_0 f f_d1 f_d2 g g_d1 g_d2 t y0 a0 b bu th thu v0
      = Gen.adj_gp_s_diagonal_11_en_out_0_0 g g_d1 g_d11 g_d12 g_d2 g_d22 t y0 a0 b bu th thu v0 ∧
    Gen.adj_fgp_s_diagonal_11_en_gp_0_1 f f_d1 f_d2 g g_d1 g_d2 t y0 a0 b bu th thu v0
      = Gen.adj_gp_s_diagonal_11_en_out_0_1 g g_d1 g_d11 g_d12 g_d2 g_d22 t y0 a0 b bu th thu v0 ∧
    Gen.adj_fgp_s_diagonal_11_en_gp_0_2 f f_d1 f_d2 g g_d1 g_d2 t y0 a0 b bu th thu v0
      = Gen.adj_gp_s_diagonal_11_en_out_0_2 g g_d1 g_d11 g_d12 g_d2 g_d22 t y0 a0 b bu th thu v0 ∧
    Gen.adj_fgp_s_diagonal_11_en_gp_0_3 f f_d1 f_d2 g g_d1 g_d2 t y0 a0 b bu th thu v0
      = Gen.adj_gp_s_diagonal_11_en_out_0_3 g g_d1 g_d11 g_d12 g_d2 g_d22 t y0 a0 b bu th thu v0 := by
  refine ⟨?_, ?_, ?_, ?_, ?_, ?_, ?_, ?_⟩ <;> simp only [Gen.adj_fgp_s_diagonal_11_en_f_0_0, Gen.adj_f_s_diagonal_11_en_out_0_0, Gen.adj_fgp_s_diagonal_11_en_f_0_1, Gen.adj_f_s_diagonal_11_en_out_0_1, Gen.adj_fgp_s_diagonal_11_en_f_0_2, Gen.adj_f_s_diagonal_11_en_out_0_2, Gen.adj_fgp_s_diagonal_11_en_f_0_3, Gen.adj_f_s_diagonal_11_en_out_0_3, Gen.adj_fgp_s_diagonal_11_en_gp_0_0, Gen.adj_gp_s_diagonal_11_en_out_0_0, Gen.adj_fgp_s_diagonal_11_en_gp_0_1, Gen.adj_gp_s_diagonal_11_en_out_0_1, Gen.adj_fgp_s_diagonal_11_en_gp_0_2, Gen.adj_gp_s_diagonal_11_en_out_0_2, Gen.adj_fgp_s_diagonal_11_en_gp_0_3, Gen.adj_gp_s_diagonal_11_en_out_0_3] <;> ring

theorem adj_fgp_s_diagonal_11_en_graph (f : K → K → K → K) (f_d1 : K → K → K → K) (f_d2 : K → K → K → K) (g : K → K → K → K) (g_d1 : K → K → K → K) (g_d11 : K → K → K → K) (g_d12 : K → K → K → K) (g_d2 : K → K → K → K) (t y0 a0 b bu th thu v0 : K) :
    Gen.adj_fgp_s_diagonal_11_en_rg_f f f_d1 f_d2 g g_d1 g_d2 t y0 a0 b bu th thu v0 = 1 ∧
    Gen.adj_fgp_s_diagonal_11_en_leaf_f f f_d1 f_d2 g g_d1 g_d2 t y0 a0 b bu th thu v0 = 0 ∧
    Gen.adj_fgp_s_diagonal_11_en_rg_gp f f_d1 f_d2 g g_d1 g_d2 t y0 a0 b bu th thu v0 = 1 ∧
    Gen.adj_fgp_s_diagonal_11_en_leaf_gp f f_d1 f_d2 g g_d1 g_d2 t y0 a0 b bu th thu v0 = 0 ∧
    Gen.adj_fgp_s_diagonal_11_en_rg_z_after f f_d1 f_d2 g g_d1 g_d2 t y0 a0 b bu th thu v0 = 1 ∧
    Gen.adj_fgp_s_diagonal_11_en_leaf_z_after f f_d1 f_d2 g g_d1 g_d2 t y0 a0 b bu th thu v0 = 1 := by
  refine ⟨?_, ?_, ?_, ?_, ?_, ?_⟩ <;> simp only [Gen.adj_fgp_s_diagonal_11_en_rg_f, Gen.adj_fgp_s_diagonal_11_en_leaf_f, Gen.adj_fgp_s_diagonal_11_en_rg_gp, Gen.adj_fgp_s_diagonal_11_en_leaf_gp, Gen.adj_fgp_s_diagonal_11_en_rg_z_after, Gen.adj_fgp_s_diagonal_11_en_leaf_z_after]

theorem adj_gdg_s_diagonal_11_ng_spec (f : K → K → K → K) (f_d1 : K → K → K → K) (f_d2 : K → K → K → K) (g : K → K → K → K) (g_d1 : K → K → K → K) (g_d11 : K → K → K → K) (g_d12 : K → K → K → K) (g_d2 : K → K → K → K) (t y0 a0 b bu th thu w0 v0 : K) :
    Gen.adj_gdg_s_diagonal_11_ng_gp_0_0 g g_d1 g_d11 g_d12 g_d2 t y0 a0 b bu th thu w0 v0
      = gProdY (jet_diagonal_11 f f_d1 f_d2 g g_d1 g_d11 g_d12 g_d2 t y0 th) ![w0] 0 ∧
    Gen.adj_gdg_s_diagonal_11_ng_gp_0_1 g g_d1 g_d11 g_d12 g_d2 t y0 a0 b bu th thu w0 v0
      = gProdA (jet_diagonal_11 f f_d1 f_d2 g g_d1 g_d11 g_d12 g_d2 t y0 th) ![a0] ![w0] 0 ∧
    Gen.adj_gdg_s_diagonal_11_ng_gp_0_2 g g_d1 g_d11 g_d12 g_d2 t y0 a0 b bu th thu w0 v0
      = gProdTh (jet_diagonal_11 f f_d1 f_d2 g g_d1 g_d11 g_d12 g_d2 t y0 th) ![a0] ![w0] 0 ∧
    Gen.adj_gdg_s_diagonal_11_ng_gp_0_3 g g_d1 g_d11 g_d12 g_d2 t y0 a0 b bu th thu w0 v0
      = gProdTh (jet_diagonal_11 f f_d1 f_d2 g g_d1 g_d11 g_d12 g_d2 t y0 th) ![a0] ![w0] 1 ∧
    Gen.adj_gdg_s_diagonal_11_ng_gdg_0_0 g g_d1 g_d11 g_d12 g_d2 t y0 a0 b bu th thu w0 v0
      = gdgY (jet_diagonal_11 f f_d1 f_d2 g g_d1 g_d11 g_d12 g_d2 t y0 th) ![v0] 0 ∧
    Gen.adj_gdg_s_diagonal_11_ng_gdg_0_1 g g_d1 g_d11 g_d12 g_d2 t y0 a0 b bu th thu w0 v0
      = gdgA (jet_diagonal_11 f f_d1 f_d2 g g_d1 g_d11 g_d12 g_d2 t y0 th) ![a0] ![v0] 0 ∧
    Gen.adj_gdg_s_diagonal_11_ng_gdg_0_2 g g_d1 g_d11 g_d12 g_d2 t y0 a0 b bu th thu w0 v0
      = gdgTh (jet_diagonal_11 f f_d1 f_d2 g g_d1 g_d11 g_d12 g_d2 t y0 th) ![a0] ![v0] 0 ∧
    Gen.adj_gdg_s_diagonal_11_ng_gdg_0_3 g g_d1 g_d11 g_d12 g_d2 t y0 a0 b bu th thu w0 v0
      = gdgTh (jet_diagonal_11 f f_d1 f_d2 g g_d1 g_d11 g_d12 g_d2 t y0 th) ![a0] ![v0] 1 := by
  refine ⟨?_, ?_, ?_, ?_, ?_, ?_, ?_, ?_⟩ <;>
  simp [Gen.adj_gdg_s_diagonal_11_ng_gp_0_0, Gen.adj_gdg_s_diagonal_11_ng_gp_0_1, Gen.adj_gdg_s_diagonal_11_ng_gp_0_2, Gen.adj_gdg_s_diagonal_11_ng_gp_0_3, Gen.adj_gdg_s_diagonal_11_ng_gdg_0_0, Gen.adj_gdg_s_diagonal_11_ng_gdg_0_1, Gen.adj_gdg_s_diagonal_11_ng_gdg_0_2, Gen.adj_gdg_s_diagonal_11_ng_gdg_0_3, jet_diagonal_11, stratDriftY, stratDriftA, stratDriftTh, itoDriftY, itoDriftA, itoDriftTh, gProdY, gProdA, gProdTh, gdgY, gdgA, gdgTh, driftY, driftA, driftTh, diffY, diffA, diffTh, itoCorr, itoCorrY, itoCorrTh, fStrat, fStratY, fStratTh, colCorrY, colCorrA, colCorrTh, Fin.sum_univ_two, Fin.sum_univ_one, Fin.isValue, Matrix.cons_val_zero, Matrix.cons_val_one, Matrix.cons_val_fin_one, Matrix.head_cons] <;> ring

theorem adj_gdg_s_diagonal_11_ng_unused_param_zero (f : K → K → K → K) (f_d1 : K → K → K → K) (f_d2 : K → K → K → K) (g : K → K → K → K) (g_d1 : K → K → K → K) (g_d11 : K → K → K → K) (g_d12 : K → K → K → K) (g_d2 : K → K → K → K) (t y0 a0 b bu th thu w0 v0 : K) :
    Gen.adj_gdg_s_diagonal_11_ng_gp_0_3 g g_d1 g_d11 g_d12 g_d2 t y0 a0 b bu th thu w0 v0 = 0 ∧
    Gen.adj_gdg_s_diagonal_11_ng_gdg_0_3 g g_d1 g_d11 g_d12 g_d2 t y0 a0 b bu th thu w0 v0 = 0 := by
  refine ⟨?_, ?_⟩ <;> simp [Gen.adj_gdg_s_diagonal_11_ng_gp_0_3, Gen.adj_gdg_s_diagonal_11_ng_gdg_0_3]

theorem adj_gdg_s_diagonal_11_ng_pair (f : K → K → K → K) (f_d1 : K → K → K → K) (f_d2 : K → K → K → K) (g : K → K → K → K) (g_d1 : K → K → K → K) (g_d11 : K → K → K → K) (g_d12 : K → K → K → K) (g_d2 : K → K → K → K) (t y0 a0 b bu th thu w0 v0 : K) :
    Gen.adj_gdg_s_diagonal_11_ng_gp_0_0 g g_d1 g_d11 g_d12 g_d2 t y0 a0 b bu th thu w0 v0
      = Gen.adj_gp_s_diagonal_11_ng_out_0_0 g g_d1 g_d2 t y0 a0 b bu th thu w0 ∧
    Gen.adj_gdg_s_diagonal_11_ng_gp_0_1 g g_d1 g_d11 g_d12 g_d2 t y0 a0 b bu th thu w0 v0
      = Gen.adj_gp_s_diagonal_11_ng_out_0_1 g g_d1 g_d2 t y0 a0 b bu th thu w0 ∧
    Gen.adj_gdg_s_diagonal_11_ng_gp_0_2 g g_d1 g_d11 g_d12 g_d2 t y0 a0 b bu th thu w0 v0
      = Gen.adj_gp_s_diagonal_11_ng_out_0_2 g g_d1 g_d2 t y0 a0 b bu th thu w0 ∧
    Gen.adj_gdg_s_diagonal_11_ng_gp_0_3 g g_d1 g_d11 g_d12 g_d2 t y0 a0 b bu th thu w0 v0
      = Gen.adj_gp_s_diagonal_11_ng_out_0_3 g g_d1 g_d2 t y0 a0 b bu th thu w0 := by
  refine ⟨?_, ?_, ?_, ?_⟩ <;> simp only [Gen.adj_gdg_s_diagonal_11_ng_gp_0_0, Gen.adj_gp_s_diagonal_11_ng_out_0_0, Gen.adj_gdg_s_diagonal_11_ng_gp_0_1, Gen.adj_gp_s_diagonal_11_ng_out_0_1, Gen.adj_gdg_s_diagonal_11_ng_gp_0_2, Gen.adj_gp_s_diagonal_11_ng_out_0_2, Gen.adj_gdg_s_diagonal_11_ng_gp_0_3, Gen.adj_gp_s_diagonal_11_ng_out_0_3] <;> ring

theorem adj_gdg_s_diagonal_11_ng_graph (f : K → K → K → K) (f_d1 : K → K → K → K) (f_d2 : K → K → K → K) (g : K → K → K → K) (g_d1 : K → K → K → K) (g_d11 : K → K → K → K) (g_d12 : K → K → K → K) (g_d2 : K → K → K → K) (t y0 a0 b bu th thu w0 v0 : K) :
    Gen.adj_gdg_s_diagonal_11_ng_rg_gp g g_d1 g_d11 g_d12 g_d2 t y0 a0 b bu th thu w0 v0 = 0 ∧
    Gen.adj_gdg_s_diagonal_11_ng_leaf_gp g g_d1 g_d11 g_d12 g_d2 t y0 a0 b bu th thu w0 v0 = 1 ∧
    Gen.adj_gdg_s_diagonal_11_ng_rg_gdg g g_d1 g_d11 g_d12 g_d2 t y0 a0 b bu th thu w0 v0 = 0 ∧
    Gen.adj_gdg_s_diagonal_11_ng_leaf_gdg g g_d1 g_d11 g_d12 g_d2 t y0 a0 b bu th thu w0 v0 = 1 ∧
    Gen.adj_gdg_s_diagonal_11_ng_rg_z_after g g_d1 g_d11 g_d12 g_d2 t y0 a0 b bu th thu w0 v0 = 0 ∧
    Gen.adj_gdg_s_diagonal_11_ng_leaf_z_after g g_d1 g_d11 g_d12 g_d2 t y0 a0 b bu th thu w0 v0 = 1 := by
  refine ⟨?_, ?_, ?_, ?_, ?_, ?_⟩ <;> simp only [Gen.adj_gdg_s_diagonal_11_ng_rg_gp, Gen.adj_gdg_s_diagonal_11_ng_leaf_gp, Gen.adj_gdg_s_diagonal_11_ng_rg_gdg, Gen.adj_gdg_s_diagonal_11_ng_leaf_gdg, Gen.adj_gdg_s_diagonal_11_ng_rg_z_after, Gen.adj_gdg_s_diagonal_11_ng_leaf_z_after]

theorem adj_gdg_s_diagonal_11_en_spec (f : K → K → K → K) (f_d1 : K → K → K → K) (f_d2 : K → K → K → K) (g : K → K → K → K) (g_d1 : K → K → K → K) (g_d11 : K → K → K → K) (g_d111 : K → K → K → K) (g_d112 : K → K → K → K) (g_d12 : K → K → K → K) (g_d122 : K → K → K → K) (g_d2 : K → K → K → K) (g_d22 : K → K → K → K) (t y0 a0 b bu th thu w0 v0 : K) :
    Gen.adj_gdg_s_diagonal_11_en_gp_0_0 g g_d1 g_d11 g_d111 g_d112 g_d12 g_d122 g_d2 g_d22 t y0 a0 b bu th thu w0 v0
      = gProdY (jet_diagonal_11 f f_d1 f_d2 g g_d1 g_d11 g_d12 g_d2 t y0 th) ![w0] 0 ∧
    Gen.adj_gdg_s_diagonal_11_en_gp_0_1 g g_d1 g_d11 g_d111 g_d112 g_d12 g_d122 g_d2 g_d22 t y0 a0 b bu th thu w0 v0
      = gProdA (jet_diagonal_11 f f_d1 f_d2 g g_d1 g_d11 g_d12 g_d2 t y0 th) ![a0] ![w0] 0 ∧
    Gen.adj_gdg_s_diagonal_11_en_gp_0_2 g g_d1 g_d11 g_d111 g_d112 g_d12 g_d122 g_d2 g_d22 t y0 a0 b bu th thu w0 v0
      = gProdTh (jet_diagonal_11 f f_d1 f_d2 g g_d1 g_d11 g_d12 g_d2 t y0 th) ![a0] ![w0] 0 ∧
    Gen.adj_gdg_s_diagonal_11_en_gp_0_3 g g_d1 g_d11 g_d111 g_d112 g_d12 g_d122 g_d2 g_d22 t y0 a0 b bu th thu w0 v0
      = gProdTh (jet_diagonal_11 f f_d1 f_d2 g g_d1 g_d11 g_d12 g_d2 t y0 th) ![a0] ![w0] 1 ∧
    Gen.adj_gdg_s_diagonal_11_en_gdg_0_0 g g_d1 g_d11 g_d111 g_d112 g_d12 g_d122 g_d2 g_d22 t y0 a0 b bu th thu w0 v0
      = gdgY (jet_diagonal_11 f f_d1 f_d2 g g_d1 g_d11 g_d12 g_d2 t y0 th) ![v0] 0 ∧
    Gen.adj_gdg_s_diagonal_11_en_gdg_0_1 g g_d1 g_d11 g_d111 g_d112 g_d12 g_d122 g_d2 g_d22 t y0 a0 b bu th thu w0 v0
      = gdgA (jet_diagonal_11 f f_d1 f_d2 g g_d1 g_d11 g_d12 g_d2 t y0 th) ![a0] ![v0] 0 ∧
    Gen.adj_gdg_s_diagonal_11_en_gdg_0_2 g g_d1 g_d11 g_d111 g_d112 g_d12 g_d122 g_d2 g_d22 t y0 a0 b bu th thu w0 v0
      = gdgTh (jet_diagonal_11 f f_d1 f_d2 g g_d1 g_d11 g_d12 g_d2 t y0 th) ![a0] ![v0] 0 ∧
    Gen.adj_gdg_s_diagonal_11_en_gdg_0_3 g g_d1 g_d11 g_d111 g_d112 g_d12 g_d122 g_d2 g_d22 t y0 a0 b bu th thu w0 v0
      = gdgTh (jet_diagonal_11 f f_d1 f_d2 g g_d1 g_d11 g_d12 g_d2 t y0 th) ![a0] ![v0] 1 := by
  refine ⟨?_, ?_, ?_, ?_, ?_, ?_, ?_, ?_⟩ <;>
  simp [Gen.adj_gdg_s_diagonal_11_en_gp_0_0, Gen.adj_gdg_s_diagonal_11_en_gp_0_1, Gen.adj_gdg_s_diagonal_11_en_gp_0_2, Gen.adj_gdg_s_diagonal_11_en_gp_0_3, Gen.adj_gdg_s_diagonal_11_en_gdg_0_0, Gen.adj_gdg_s_diagonal_11_en_gdg_0_1, Gen.adj_gdg_s_diagonal_11_en_gdg_0_2, Gen.adj_gdg_s_diagonal_11_en_gdg_0_3, jet_diagonal_11, stratDriftY, stratDriftA, stratDriftTh, itoDriftY, itoDriftA, itoDriftTh, gProdY, gProdA, gProdTh, gdgY, gdgA, gdgTh, driftY, driftA, driftTh, diffY, diffA, diffTh, itoCorr, itoCorrY, itoCorrTh, fStrat, fStratY, fStratTh, colCorrY, colCorrA, colCorrTh, Fin.sum_univ_two, Fin.sum_univ_one, Fin.isValue, Matrix.cons_val_zero, Matrix.cons_val_one, Matrix.cons_val_fin_one, Matrix.head_cons] <;> ring

theorem adj_gdg_s_diagonal_11_en_unused_param_zero (f : K → K → K → K) (f_d1 : K → K → K → K) (f_d2 : K → K → K → K) (g : K → K → K → K) (g_d1 : K → K → K → K) (g_d11 : K → K → K → K) (g_d111 : K → K → K → K) (g_d112 : K → K → K → K) (g_d12 : K → K → K → K) (g_d122 : K → K → K → K) (g_d2 : K → K → K → K) (g_d22 : K → K → K → K) (t y0 a0 b bu th thu w0 v0 : K) :
    Gen.adj_gdg_s_diagonal_11_en_gp_0_3 g g_d1 g_d11 g_d111 g_d112 g_d12 g_d122 g_d2 g_d22 t y0 a0 b bu th thu w0 v0 = 0 ∧
    Gen.adj_gdg_s_diagonal_11_en_gdg_0_3 g g_d1 g_d11 g_d111 g_d112 g_d12 g_d122 g_d2 g_d22 t y0 a0 b bu th thu w0 v0 = 0 := by
  refine ⟨?_, ?_⟩ <;> simp [Gen.adj_gdg_s_diagonal_11_en_gp_0_3, Gen.adj_gdg_s_diagonal_11_en_gdg_0_3]

theorem adj_gdg_s_diagonal_11_en_pair (f : K → K → K → K) (f_d1 : K → K → K → K) (f_d2 : K → K → K → K) (g : K → K → K → K) (g_d1 : K → K → K → K) (g_d11 : K → K → K → K) (g_d111 : K → K → K → K) (g_d112 : K → K → K → K) (g_d12 : K → K → K → K) (g_d122 : K → K → K → K) (g_d2 : K → K → K → K) (g_d22 : K → K → K → K) (t y0 a0 b bu th thu w0 v0 : K) :
    Gen.adj_gdg_s_diagonal_11_en_gp_0_0 g g_d1 g_d11 g_d111 g_d112 g_d12 g_d122 g_d2 g_d22 t y0 a0 b bu th thu w0 v0
      = Gen.adj_gp_s_diagonal_11_en_out_0_0 g g_d1 g_d11 g_d12 g_d2 g_d22 t y0 a0 b bu th thu w0 ∧
    Gen.adj_gdg_s_diagonal_11_en_gp_0_1 g g_d1 g_d11 g_d111 g_d112 g_d12 g_d122 g_d2 g_d22 t y0 a0 b bu th thu w0 v0
      = Gen.adj_gp_s_diagonal_11_en_out_0_1 g g_d1 g_d11 g_d12 g_d2 g_d22 t y0 a0 b bu th thu w0 ∧
    Gen.adj_gdg_s_diagonal_11_en_gp_0_2 g g_d1 g_d11 g_d111 g_d112 g_d12 g_d122 g_d2 g_d22 t y0 a0 b bu th thu w0 v0
      = Gen.adj_gp_s_diagonal_11_en_out_0_2 g g_d1 g_d11 g_d12 g_d2 g_d22 t y0 a0 b bu th thu w0 ∧
    Gen.adj_gdg_s_diagonal_11_en_gp_0_3 g g_d1 g_d11 g_d111 g_d112 g_d12 g_d122 g_d2 g_d22 t y0 a0 b bu th thu w0 v0
      = Gen.adj_gp_s_diagonal_11_en_out_0_3 g g_d1 g_d11 g_d12 g_d2 g_d22 t y0 a0 b bu th thu w0 := by
  refine ⟨?_, ?_, ?_, ?_⟩ <;> simp only [Gen.adj_gdg_s_diagonal_11_en_gp_0_0, Gen.adj_gp_s_diagonal_11_en_out_0_0, Gen.adj_gdg_s_diagonal_11_en_gp_0_1, Gen.adj_gp_s_diagonal_11_en_out_0_1, Gen.adj_gdg_s_diagonal_11_en_gp_0_2, Gen.adj_gp_s_diagonal_11_en_out_0_2, Gen.adj_gdg_s_diagonal_11_en_gp_0_3, Gen.adj_gp_s_diagonal_11_en_out_0_3] <;> ring

theorem adj_gdg_s_diagonal_11_en_graph (f : K → K → K → K) (f_d1 : K → K → K → K) (f_d2 : K → K → K → K) (g : K → K → K → K) (g_d1 : K → K → K → K) (g_d11 : K → K → K → K) (g_d111 : K → K → K → K) (g_d112 : K → K → K → K) (g_d12 : K → K → K → K) (g_d122 : K → K → K → K) (g_d2 : K → K → K → K) (g_d22 : K → K → K → K) (t y0 a0 b bu th thu w0 v0 : K) :
    Gen.adj_gdg_s_diagonal_11_en_rg_gp g g_d1 g_d11 g_d111 g_d112 g_d12 g_d122 g_d2 g_d22 t y0 a0 b bu th thu w0 v0 = 1 ∧
    Gen.adj_gdg_s_diagonal_11_en_leaf_gp g g_d1 g_d11 g_d111 g_d112 g_d12 g_d122 g_d2 g_d22 t y0 a0 b bu th thu w0 v0 = 0 ∧
    Gen.adj_gdg_s_diagonal_11_en_rg_gdg g g_d1 g_d11 g_d111 g_d112 g_d12 g_d122 g_d2 g_d22 t y0 a0 b bu th thu w0 v0 = 1 ∧
    Gen.adj_gdg_s_diagonal_11_en_leaf_gdg g g_d1 g_d11 g_d111 g_d112 g_d12 g_d122 g_d2 g_d22 t y0 a0 b bu th thu w0 v0 = 0 ∧
    Gen.adj_gdg_s_diagonal_11_en_rg_z_after g g_d1 g_d11 g_d111 g_d112 g_d12 g_d122 g_d2 g_d22 t y0 a0 b bu th thu w0 v0 = 1 ∧
    Gen.adj_gdg_s_diagonal_11_en_leaf_z_after g g_d1 g_d11 g_d111 g_d112 g_d12 g_d122 g_d2 g_d22 t y0 a0 b bu th thu w0 v0 = 1 := by
  refine ⟨?_, ?_, ?_, ?_, ?_, ?_⟩ <;> simp only [Gen.adj_gdg_s_diagonal_11_en_rg_gp, Gen.adj_gdg_s_diagonal_11_en_leaf_gp, Gen.adj_gdg_s_diagonal_11_en_rg_gdg, Gen.adj_gdg_s_diagonal_11_en_leaf_gdg, Gen.adj_gdg_s_diagonal_11_en_rg_z_after, Gen.adj_gdg_s_diagonal_11_en_leaf_z_after]

theorem adj_f_s_diagonal_22_ng_spec (f0 : K → K → K → K → K) (f0_d1 : K → K → K → K → K) (f0_d2 : K → K → K → K → K) (f0_d3 : K → K → K → K → K) (f1 : K → K → K → K → K) (f1_d1 : K → K → K → K → K) (f1_d2 : K → K → K → K → K) (f1_d3 : K → K → K → K → K) (g0 : K → K → K → K) (g0_d1 : K → K → K → K) (g0_d11 : K → K → K → K) (g0_d12 : K → K → K → K) (g0_d2 : K → K → K → K) (g1 : K → K → K → K) (g1_d1 : K → K → K → K) (g1_d11 : K → K → K → K) (g1_d12 : K → K → K → K) (g1_d2 : K → K → K → K) (t y0 y1 a0 a1 b bu th thu : K) :
    Gen.adj_f_s_diagonal_22_ng_out_0_0 f0 f0_d1 f0_d2 f0_d3 f1 f1_d1 f1_d2 f1_d3 t y0 y1 a0 a1 b bu th thu
      = stratDriftY (jet_diagonal_22 f0 f0_d1 f0_d2 f0_d3 f1 f1_d1 f1_d2 f1_d3 g0 g0_d1 g0_d11 g0_d12 g0_d2 g1 g1_d1 g1_d11 g1_d12 g1_d2 t y0 y1 th) 0 ∧
    Gen.adj_f_s_diagonal_22_ng_out_0_1 f0 f0_d1 f0_d2 f0_d3 f1 f1_d1 f1_d2 f1_d3 t y0 y1 a0 a1 b bu th thu
      = stratDriftY (jet_diagonal_22 f0 f0_d1 f0_d2 f0_d3 f1 f1_d1 f1_d2 f1_d3 g0 g0_d1 g0_d11 g0_d12 g0_d2 g1 g1_d1 g1_d11 g1_d12 g1_d2 t y0 y1 th) 1 ∧
    Gen.adj_f_s_diagonal_22_ng_out_0_2 f0 f0_d1 f0_d2 f0_d3 f1 f1_d1 f1_d2 f1_d3 t y0 y1 a0 a1 b bu th thu
      = stratDriftA (jet_diagonal_22 f0 f0_d1 f0_d2 f0_d3 f1 f1_d1 f1_d2 f1_d3 g0 g0_d1 g0_d11 g0_d12 g0_d2 g1 g1_d1 g1_d11 g1_d12 g1_d2 t y0 y1 th) ![a0, a1] 0 ∧
    Gen.adj_f_s_diagonal_22_ng_out_0_3 f0 f0_d1 f0_d2 f0_d3 f1 f1_d1 f1_d2 f1_d3 t y0 y1 a0 a1 b bu th thu
      = stratDriftA (jet_diagonal_22 f0 f0_d1 f0_d2 f0_d3 f1 f1_d1 f1_d2 f1_d3 g0 g0_d1 g0_d11 g0_d12 g0_d2 g1 g1_d1 g1_d11 g1_d12 g1_d2 t y0 y1 th) ![a0, a1] 1 ∧
    Gen.adj_f_s_diagonal_22_ng_out_0_4 f0 f0_d1 f0_d2 f0_d3 f1 f1_d1 f1_d2 f1_d3 t y0 y1 a0 a1 b bu th thu
      = stratDriftTh (jet_diagonal_22 f0 f0_d1 f0_d2 f0_d3 f1 f1_d1 f1_d2 f1_d3 g0 g0_d1 g0_d11 g0_d12 g0_d2 g1 g1_d1 g1_d11 g1_d12 g1_d2 t y0 y1 th) ![a0, a1] 0 ∧
    Gen.adj_f_s_diagonal_22_ng_out_0_5 f0 f0_d1 f0_d2 f0_d3 f1 f1_d1 f1_d2 f1_d3 t y0 y1 a0 a1 b bu th thu
      = stratDriftTh (jet_diagonal_22 f0 f0_d1 f0_d2 f0_d3 f1 f1_d1 f1_d2 f1_d3 g0 g0_d1 g0_d11 g0_d12 g0_d2 g1 g1_d1 g1_d11 g1_d12 g1_d2 t y0 y1 th) ![a0, a1] 1 := by
  refine ⟨?_, ?_, ?_, ?_, ?_, ?_⟩ <;>
  simp [Gen.adj_f_s_diagonal_22_ng_out_0_0, Gen.adj_f_s_diagonal_22_ng_out_0_1, Gen.adj_f_s_diagonal_22_ng_out_0_2, Gen.adj_f_s_diagonal_22_ng_out_0_3, Gen.adj_f_s_diagonal_22_ng_out_0_4, Gen.adj_f_s_diagonal_22_ng_out_0_5, jet_diagonal_22, stratDriftY, stratDriftA, stratDriftTh, itoDriftY, itoDriftA, itoDriftTh, gProdY, gProdA, gProdTh, gdgY, gdgA, gdgTh, driftY, driftA, driftTh, diffY, diffA, diffTh, itoCorr, itoCorrY, itoCorrTh, fStrat, fStratY, fStratTh, colCorrY, colCorrA, colCorrTh, Fin.sum_univ_two, Fin.sum_univ_one, Fin.isValue, Matrix.cons_val_zero, Matrix.cons_val_one, Matrix.cons_val_fin_one, Matrix.head_cons] <;> ring

theorem adj_f_s_diagonal_22_ng_unused_param_zero (f0 : K → K → K → K → K) (f0_d1 : K → K → K → K → K) (f0_d2 : K → K → K → K → K) (f0_d3 : K → K → K → K → K) (f1 : K → K → K → K → K) (f1_d1 : K → K → K → K → K) (f1_d2 : K → K → K → K → K) (f1_d3 : K → K → K → K → K) (g0 : K → K → K → K) (g0_d1 : K → K → K → K) (g0_d11 : K → K → K → K) (g0_d12 : K → K → K → K) (g0_d2 : K → K → K → K) (g1 : K → K → K → K) (g1_d1 : K → K → K → K) (g1_d11 : K → K → K → K) (g1_d12 : K → K → K → K) (g1_d2 : K → K → K → K) (t y0 y1 a0 a1 b bu th thu : K) :
    Gen.adj_f_s_diagonal_22_ng_out_0_5 f0 f0_d1 f0_d2 f0_d3 f1 f1_d1 f1_d2 f1_d3 t y0 y1 a0 a1 b bu th thu = 0 := by
  simp [Gen.adj_f_s_diagonal_22_ng_out_0_5]

theorem adj_f_s_diagonal_22_ng_graph (f0 : K → K → K → K → K) (f0_d1 : K → K → K → K → K) (f0_d2 : K → K → K → K → K) (f0_d3 : K → K → K → K → K) (f1 : K → K → K → K → K) (f1_d1 : K → K → K → K → K) (f1_d2 : K → K → K → K → K) (f1_d3 : K → K → K → K → K) (g0 : K → K → K → K) (g0_d1 : K → K → K → K) (g0_d11 : K → K → K → K) (g0_d12 : K → K → K → K) (g0_d2 : K → K → K → K) (g1 : K → K → K → K) (g1_d1 : K → K → K → K) (g1_d11 : K → K → K → K) (g1_d12 : K → K → K → K) (g1_d2 : K → K → K → K) (t y0 y1 a0 a1 b bu th thu : K) :
    Gen.adj_f_s_diagonal_22_ng_rg_out f0 f0_d1 f0_d2 f0_d3 f1 f1_d1 f1_d2 f1_d3 t y0 y1 a0 a1 b bu th thu = 0 ∧
    Gen.adj_f_s_diagonal_22_ng_leaf_out f0 f0_d1 f0_d2 f0_d3 f1 f1_d1 f1_d2 f1_d3 t y0 y1 a0 a1 b bu th thu = 1 ∧
    Gen.adj_f_s_diagonal_22_ng_rg_z_after f0 f0_d1 f0_d2 f0_d3 f1 f1_d1 f1_d2 f1_d3 t y0 y1 a0 a1 b bu th thu = 0 ∧
    Gen.adj_f_s_diagonal_22_ng_leaf_z_after f0 f0_d1 f0_d2 f0_d3 f1 f1_d1 f1_d2 f1_d3 t y0 y1 a0 a1 b bu th thu = 1 := by
  refine ⟨?_, ?_, ?_, ?_⟩ <;> simp only [Gen.adj_f_s_diagonal_22_ng_rg_out, Gen.adj_f_s_diagonal_22_ng_leaf_out, Gen.adj_f_s_diagonal_22_ng_rg_z_after, Gen.adj_f_s_diagonal_22_ng_leaf_z_after]

theorem adj_f_s_diagonal_22_en_spec (f0 : K → K → K → K → K) (f0_d1 : K → K → K → K → K) (f0_d2 : K → K → K → K → K) (f0_d3 : K → K → K → K → K) (f1 : K → K → K → K → K) (f1_d1 : K → K → K → K → K) (f1_d2 : K → K → K → K → K) (f1_d3 : K → K → K → K → K) (g0 : K → K → K → K) (g0_d1 : K → K → K → K) (g0_d11 : K → K → K → K) (g0_d12 : K → K → K → K) (g0_d2 : K → K → K → K) (g1 : K → K → K → K) (g1_d1 : K → K → K → K) (g1_d11 : K → K → K → K) (g1_d12 : K → K → K → K) (g1_d2 : K → K → K → K) (t y0 y1 a0 a1 b bu th thu : K) :
    Gen.adj_f_s_diagonal_22_en_out_0_0 f0 f0_d1 f0_d2 f0_d3 f1 f1_d1 f1_d2 f1_d3 t y0 y1 a0 a1 b bu th thu
      = stratDriftY (jet_diagonal_22 f0 f0_d1 f0_d2 f0_d3 f1 f1_d1 f1_d2 f1_d3 g0 g0_d1 g0_d11 g0_d12 g0_d2 g1 g1_d1 g1_d11 g1_d12 g1_d2 t y0 y1 th) 0 ∧
    Gen.adj_f_s_diagonal_22_en_out_0_1 f0 f0_d1 f0_d2 f0_d3 f1 f1_d1 f1_d2 f1_d3 t y0 y1 a0 a1 b bu th thu
      = stratDriftY (jet_diagonal_22 f0 f0_d1 f0_d2 f0_d3 f1 f1_d1 f1_d2 f1_d3 g0 g0_d1 g0_d11 g0_d12 g0_d2 g1 g1_d1 g1_d11 g1_d12 g1_d2 t y0 y1 th) 1 ∧
    Gen.adj_f_s_diagonal_22_en_out_0_2 f0 f0_d1 f0_d2 f0_d3 f1 f1_d1 f1_d2 f1_d3 t y0 y1 a0 a1 b bu th thu
      = stratDriftA (jet_diagonal_22 f0 f0_d1 f0_d2 f0_d3 f1 f1_d1 f1_d2 f1_d3 g0 g0_d1 g0_d11 g0_d12 g0_d2 g1 g1_d1 g1_d11 g1_d12 g1_d2 t y0 y1 th) ![a0, a1] 0 ∧
    Gen.adj_f_s_diagonal_22_en_out_0_3 f0 f0_d1 f0_d2 f0_d3 f1 f1_d1 f1_d2 f1_d3 t y0 y1 a0 a1 b bu th thu
      = stratDriftA (jet_diagonal_22 f0 f0_d1 f0_d2 f0_d3 f1 f1_d1 f1_d2 f1_d3 g0 g0_d1 g0_d11 g0_d12 g0_d2 g1 g1_d1 g1_d11 g1_d12 g1_d2 t y0 y1 th) ![a0, a1] 1 ∧
    Gen.adj_f_s_diagonal_22_en_out_0_4 f0 f0_d1 f0_d2 f0_d3 f1 f1_d1 f1_d2 f1_d3 t y0 y1 a0 a1 b bu th thu
      = stratDriftTh (jet_diagonal_22 f0 f0_d1 f0_d2 f0_d3 f1 f1_d1 f1_d2 f1_d3 g0 g0_d1 g0_d11 g0_d12 g0_d2 g1 g1_d1 g1_d11 g1_d12 g1_d2 t y0 y1 th) ![a0, a1] 0 ∧
    Gen.adj_f_s_diagonal_22_en_out_0_5 f0 f0_d1 f0_d2 f0_d3 f1 f1_d1 f1_d2 f1_d3 t y0 y1 a0 a1 b bu th thu
      = stratDriftTh (jet_diagonal_22 f0 f0_d1 f0_d2 f0_d3 f1 f1_d1 f1_d2 f1_d3 g0 g0_d1 g0_d11 g0_d12 g0_d2 g1 g1_d1 g1_d11 g1_d12 g1_d2 t y0 y1 th) ![a0, a1] 1 := by
  refine ⟨?_, ?_, ?_, ?_, ?_, ?_⟩ <;>
  simp [Gen.adj_f_s_diagonal_22_en_out_0_0, Gen.adj_f_s_diagonal_22_en_out_0_1, Gen.adj_f_s_diagonal_22_en_out_0_2, Gen.adj_f_s_diagonal_22_en_out_0_3, Gen.adj_f_s_diagonal_22_en_out_0_4, Gen.adj_f_s_diagonal_22_en_out_0_5, jet_diagonal_22, stratDriftY, stratDriftA, stratDriftTh, itoDriftY, itoDriftA, itoDriftTh, gProdY, gProdA, gProdTh, gdgY, gdgA, gdgTh, driftY, driftA, driftTh, diffY, diffA, diffTh, itoCorr, itoCorrY, itoCorrTh, fStrat, fStratY, fStratTh, colCorrY, colCorrA, colCorrTh, Fin.sum_univ_two, Fin.sum_univ_one, Fin.isValue, Matrix.cons_val_zero, Matrix.cons_val_one, Matrix.cons_val_fin_one, Matrix.head_cons] <;> ring

theorem adj_f_s_diagonal_22_en_unused_param_zero (f0 : K → K → K → K → K) (f0_d1 : K → K → K → K → K) (f0_d2 : K → K → K → K → K) (f0_d3 : K → K → K → K → K) (f1 : K → K → K → K → K) (f1_d1 : K → K → K → K → K) (f1_d2 : K → K → K → K → K) (f1_d3 : K → K → K → K → K) (g0 : K → K → K → K) (g0_d1 : K → K → K → K) (g0_d11 : K → K → K → K) (g0_d12 : K → K → K → K) (g0_d2 : K → K → K → K) (g1 : K → K → K → K) (g1_d1 : K → K → K → K) (g1_d11 : K → K → K → K) (g1_d12 : K → K → K → K) (g1_d2 : K → K → K → K) (t y0 y1 a0 a1 b bu th thu : K) :
    Gen.adj_f_s_diagonal_22_en_out_0_5 f0 f0_d1 f0_d2 f0_d3 f1 f1_d1 f1_d2 f1_d3 t y0 y1 a0 a1 b bu th thu = 0 := by
  simp [Gen.adj_f_s_diagonal_22_en_out_0_5]

theorem adj_f_s_diagonal_22_en_graph (f0 : K → K → K → K → K) (f0_d1 : K → K → K → K → K) (f0_d2 : K → K → K → K → K) (f0_d3 : K → K → K → K → K) (f1 : K → K → K → K → K) (f1_d1 : K → K → K → K → K) (f1_d2 : K → K → K → K → K) (f1_d3 : K → K → K → K → K) (g0 : K → K → K → K) (g0_d1 : K → K → K → K) (g0_d11 : K → K → K → K) (g0_d12 : K → K → K → K) (g0_d2 : K → K → K → K) (g1 : K → K → K → K) (g1_d1 : K → K → K → K) (g1_d11 : K → K → K → K) (g1_d12 : K → K → K → K) (g1_d2 : K → K → K → K) (t y0 y1 a0 a1 b bu th thu : K) :
    Gen.adj_f_s_diagonal_22_en_rg_out f0 f0_d1 f0_d2 f0_d3 f1 f1_d1 f1_d2 f1_d3 t y0 y1 a0 a1 b bu th thu = 1 ∧
    Gen.adj_f_s_diagonal_22_en_leaf_out f0 f0_d1 f0_d2 f0_d3 f1 f1_d1 f1_d2 f1_d3 t y0 y1 a0 a1 b bu th thu = 0 ∧
    Gen.adj_f_s_diagonal_22_en_rg_z_after f0 f0_d1 f0_d2 f0_d3 f1 f1_d1 f1_d2 f1_d3 t y0 y1 a0 a1 b bu th thu = 1 ∧
    Gen.adj_f_s_diagonal_22_en_leaf_z_after f0 f0_d1 f0_d2 f0_d3 f1 f1_d1 f1_d2 f1_d3 t y0 y1 a0 a1 b bu th thu = 1 := by
  refine ⟨?_, ?_, ?_, ?_⟩ <;> simp only [Gen.adj_f_s_diagonal_22_en_rg_out, Gen.adj_f_s_diagonal_22_en_leaf_out, Gen.adj_f_s_diagonal_22_en_rg_z_after, Gen.adj_f_s_diagonal_22_en_leaf_z_after]

theorem adj_gp_s_diagonal_22_ng_spec (f0 : K → K → K → K → K) (f0_d1 : K → K → K → K → K) (f0_d2 : K → K → K → K → K) (f0_d3 : K → K → K → K → K) (f1 : K → K → K → K → K) (f1_d1 : K → K → K → K → K) (f1_d2 : K → K → K → K → K) (f1_d3 : K → K → K → K → K) (g0 : K → K → K → K) (g0_d1 : K → K → K → K) (g0_d11 : K → K → K → K) (g0_d12 : K → K → K → K) (g0_d2 : K → K → K → K) (g1 : K → K → K → K) (g1_d1 : K → K → K → K) (g1_d11 : K → K → K → K) (g1_d12 : K → K → K → K) (g1_d2 : K → K → K → K) (t y0 y1 a0 a1 b bu th thu v0 v1 : K) :
    Gen.adj_gp_s_diagonal_22_ng_out_0_0 g0 g0_d1 g0_d2 g1 g1_d1 g1_d2 t y0 y1 a0 a1 b bu th thu v0 v1
      = gProdY (jet_diagonal_22 f0 f0_d1 f0_d2 f0_d3 f1 f1_d1 f1_d2 f1_d3 g0 g0_d1 g0_d11 g0_d12 g0_d2 g1 g1_d1 g1_d11 g1_d12 g1_d2 t y0 y1 th) ![v0, v1] 0 ∧
    Gen.adj_gp_s_diagonal_22_ng_out_0_1 g0 g0_d1 g0_d2 g1 g1_d1 g1_d2 t y0 y1 a0 a1 b bu th thu v0 v1
      = gProdY (jet_diagonal_22 f0 f0_d1 f0_d2 f0_d3 f1 f1_d1 f1_d2 f1_d3 g0 g0_d1 g0_d11 g0_d12 g0_d2 g1 g1_d1 g1_d11 g1_d12 g1_d2 t y0 y1 th) ![v0, v1] 1 ∧
    Gen.adj_gp_s_diagonal_22_ng_out_0_2 g0 g0_d1 g0_d2 g1 g1_d1 g1_d2 t y0 y1 a0 a1 b bu th thu v0 v1
      = gProdA (jet_diagonal_22 f0 f0_d1 f0_d2 f0_d3 f1 f1_d1 f1_d2 f1_d3 g0 g0_d1 g0_d11 g0_d12 g0_d2 g1 g1_d1 g1_d11 g1_d12 g1_d2 t y0 y1 th) ![a0, a1] ![v0, v1] 0 ∧
    Gen.adj_gp_s_diagonal_22_ng_out_0_3 g0 g0_d1 g0_d2 g1 g1_d1 g1_d2 t y0 y1 a0 a1 b bu th thu v0 v1
      = gProdA (jet_diagonal_22 f0 f0_d1 f0_d2 f0_d3 f1 f1_d1 f1_d2 f1_d3 g0 g0_d1 g0_d11 g0_d12 g0_d2 g1 g1_d1 g1_d11 g1_d12 g1_d2 t y0 y1 th) ![a0, a1] ![v0, v1] 1 ∧
    Gen.adj_gp_s_diagonal_22_ng_out_0_4 g0 g0_d1 g0_d2 g1 g1_d1 g1_d2 t y0 y1 a0 a1 b bu th thu v0 v1
      = gProdTh (jet_diagonal_22 f0 f0_d1 f0_d2 f0_d3 f1 f1_d1 f1_d2 f1_d3 g0 g0_d1 g0_d11 g0_d12 g0_d2 g1 g1_d1 g1_d11 g1_d12 g1_d2 t y0 y1 th) ![a0, a1] ![v0, v1] 0 ∧
    Gen.adj_gp_s_diagonal_22_ng_out_0_5 g0 g0_d1 g0_d2 g1 g1_d1 g1_d2 t y0 y1 a0 a1 b bu th thu v0 v1
      = gProdTh (jet_diagonal_22 f0 f0_d1 f0_d2 f0_d3 f1 f1_d1 f1_d2 f1_d3 g0 g0_d1 g0_d11 g0_d12 g0_d2 g1 g1_d1 g1_d11 g1_d12 g1_d2 t y0 y1 th) ![a0, a1] ![v0, v1] 1 := by
  refine ⟨?_, ?_, ?_, ?_, ?_, ?_⟩ <;>
  simp [Gen.adj_gp_s_diagonal_22_ng_out_0_0, Gen.adj_gp_s_diagonal_22_ng_out_0_1, Gen.adj_gp_s_diagonal_22_ng_out_0_2, Gen.adj_gp_s_diagonal_22_ng_out_0_3, Gen.adj_gp_s_diagonal_22_ng_out_0_4, Gen.adj_gp_s_diagonal_22_ng_out_0_5, jet_diagonal_22, stratDriftY, stratDriftA, stratDriftTh, itoDriftY, itoDriftA, itoDriftTh, gProdY, gProdA, gProdTh, gdgY, gdgA, gdgTh, driftY, driftA, driftTh, diffY, diffA, diffTh, itoCorr, itoCorrY, itoCorrTh, fStrat, fStratY, fStratTh, colCorrY, colCorrA, colCorrTh, Fin.sum_univ_two, Fin.sum_univ_one, Fin.isValue, Matrix.cons_val_zero, Matrix.cons_val_one, Matrix.cons_val_fin_one, Matrix.head_cons] <;> ring

theorem adj_gp_s_diagonal_22_ng_unused_param_zero (f0 : K → K → K → K → K) (f0_d1 : K → K → K → K → K) (f0_d2 : K → K → K → K → K) (f0_d3 : K → K → K → K → K) (f1 : K → K → K → K → K) (f1_d1 : K → K → K → K → K) (f1_d2 : K → K → K → K → K) (f1_d3 : K → K → K → K → K) (g0 : K → K → K → K) (g0_d1 : K → K → K → K) (g0_d11 : K → K → K → K) (g0_d12 : K → K → K → K) (g0_d2 : K → K → K → K) (g1 : K → K → K → K) (g1_d1 : K → K → K → K) (g1_d11 : K → K → K → K) (g1_d12 : K → K → K → K) (g1_d2 : K → K → K → K) (t y0 y1 a0 a1 b bu th thu v0 v1 : K) :
    Gen.adj_gp_s_diagonal_22_ng_out_0_5 g0 g0_d1 g0_d2 g1 g1_d1 g1_d2 t y0 y1 a0 a1 b bu th thu v0 v1 = 0 := by
  simp [Gen.adj_gp_s_diagonal_22_ng_out_0_5]

theorem adj_gp_s_diagonal_22_ng_graph (f0 : K → K → K → K → K) (f0_d1 : K → K → K → K → K) (f0_d2 : K → K → K → K → K) (f0_d3 : K → K → K → K → K) (f1 : K → K → K → K → K) (f1_d1 : K → K → K → K → K) (f1_d2 : K → K → K → K → K) (f1_d3 : K → K → K → K → K) (g0 : K → K → K → K) (g0_d1 : K → K → K → K) (g0_d11 : K → K → K → K) (g0_d12 : K → K → K → K) (g0_d2 : K → K → K → K) (g1 : K → K → K → K) (g1_d1 : K → K → K → K) (g1_d11 : K → K → K → K) (g1_d12 : K → K → K → K) (g1_d2 : K → K → K → K) (t y0 y1 a0 a1 b bu th thu v0 v1 : K) :
    Gen.adj_gp_s_diagonal_22_ng_rg_out g0 g0_d1 g0_d2 g1 g1_d1 g1_d2 t y0 y1 a0 a1 b bu th thu v0 v1 = 0 ∧
    Gen.adj_gp_s_diagonal_22_ng_leaf_out g0 g0_d1 g0_d2 g1 g1_d1 g1_d2 t y0 y1 a0 a1 b bu th thu v0 v1 = 1 ∧
    Gen.adj_gp_s_diagonal_22_ng_rg_z_after g0 g0_d1 g0_d2 g1 g1_d1 g1_d2 t y0 y1 a0 a1 b bu th thu v0 v1 = 0 ∧
    Gen.adj_gp_s_diagonal_22_ng_leaf_z_after g0 g0_d1 g0_d2 g1 g1_d1 g1_d2 t y0 y1 a0 a1 b bu th thu v0 v1 = 1 := by
  refine ⟨?_, ?_, ?_, ?_⟩ <;> simp only [Gen.adj_gp_s_diagonal_22_ng_rg_out, Gen.adj_gp_s_diagonal_22_ng_leaf_out, Gen.adj_gp_s_diagonal_22_ng_rg_z_after, Gen.adj_gp_s_diagonal_22_ng_leaf_z_after]

theorem adj_gp_s_diagonal_22_en_spec (f0 : K → K → K → K → K) (f0_d1 : K → K → K → K → K) (f0_d2 : K → K → K → K → K) (f0_d3 : K → K → K → K → K) (f1 : K → K → K → K → K) (f1_d1 : K → K → K → K → K) (f1_d2 : K → K → K → K → K) (f1_d3 : K → K → K → K → K) (g0 : K → K → K → K) (g0_d1 : K → K → K → K) (g0_d11 : K → K → K → K) (g0_d12 : K → K → K → K) (g0_d2 : K → K → K → K) (g1 : K → K → K → K) (g1_d1 : K → K → K → K) (g1_d11 : K → K → K → K) (g1_d12 : K → K → K → K) (g1_d2 : K → K → K → K) (t y0 y1 a0 a1 b bu th thu v0 v1 : K) :
    Gen.adj_gp_s_diagonal_22_en_out_0_0 g0 g0_d1 g0_d2 g1 g1_d1 g1_d2 t y0 y1 a0 a1 b bu th thu v0 v1
      = gProdY (jet_diagonal_22 f0 f0_d1 f0_d2 f0_d3 f1 f1_d1 f1_d2 f1_d3 g0 g0_d1 g0_d11 g0_d12 g0_d2 g1 g1_d1 g1_d11 g1_d12 g1_d2 t y0 y1 th) ![v0, v1] 0 ∧
    Gen.adj_gp_s_diagonal_22_en_out_0_1 g0 g0_d1 g0_d2 g1 g1_d1 g1_d2 t y0 y1 a0 a1 b bu th thu v0 v1
      = gProdY (jet_diagonal_22 f0 f0_d1 f0_d2 f0_d3 f1 f1_d1 f1_d2 f1_d3 g0 g0_d1 g0_d11 g0_d12 g0_d2 g1 g1_d1 g1_d11 g1_d12 g1_d2 t y0 y1 th) ![v0, v1] 1 ∧
    Gen.adj_gp_s_diagonal_22_en_out_0_2 g0 g0_d1 g0_d2 g1 g1_d1 g1_d2 t y0 y1 a0 a1 b bu th thu v0 v1
      = gProdA (jet_diagonal_22 f0 f0_d1 f0_d2 f0_d3 f1 f1_d1 f1_d2 f1_d3 g0 g0_d1 g0_d11 g0_d12 g0_d2 g1 g1_d1 g1_d11 g1_d12 g1_d2 t y0 y1 th) ![a0, a1] ![v0, v1] 0 ∧
    Gen.adj_gp_s_diagonal_22_en_out_0_3 g0 g0_d1 g0_d2 g1 g1_d1 g1_d2 t y0 y1 a0 a1 b bu th thu v0 v1
      = gProdA (jet_diagonal_22 f0 f0_d1 f0_d2 f0_d3 f1 f1_d1 f1_d2 f1_d3 g0 g0_d1 g0_d11 g0_d12 g0_d2 g1 g1_d1 g1_d11 g1_d12 g1_d2 t y0 y1 th) ![a0, a1] ![v0, v1] 1 ∧
    Gen.adj_gp_s_diagonal_22_en_out_0_4 g0 g0_d1 g0_d2 g1 g1_d1 g1_d2 t y0 y1 a0 a1 b bu th thu v0 v1
      = gProdTh (jet_diagonal_22 f0 f0_d1 f0_d2 f0_d3 f1 f1_d1 f1_d2 f1_d3 g0 g0_d1 g0_d11 g0_d12 g0_d2 g1 g1_d1 g1_d11 g1_d12 g1_d2 t y0 y1 th) ![a0, a1] ![v0, v1] 0 ∧
    Gen.adj_gp_s_diagonal_22_en_out_0_5 g0 g0_d1 g0_d2 g1 g1_d1 g1_d2 t y0 y1 a0 a1 b bu th thu v0 v1
      = gProdTh (jet_diagonal_22 f0 f0_d1 f0_d2 f0_d3 f1 f1_d1 f1_d2 f1_d3 g0 g0_d1 g0_d11 g0_d12 g0_d2 g1 g1_d1 g1_d11 g1_d12 g1_d2 t y0 y1 th) ![a0, a1] ![v0, v1] 1 := by
  refine ⟨?_, ?_, ?_, ?_, ?_, ?_⟩ <;>
  simp [Gen.adj_gp_s_diagonal_22_en_out_0_0, Gen.adj_gp_s_diagonal_22_en_out_0_1, Gen.adj_gp_s_diagonal_22_en_out_0_2, Gen.adj_gp_s_diagonal_22_en_out_0_3, Gen.adj_gp_s_diagonal_22_en_out_0_4, Gen.adj_gp_s_diagonal_22_en_out_0_5, jet_diagonal_22, stratDriftY, stratDriftA, stratDriftTh, itoDriftY, itoDriftA, itoDriftTh, gProdY, gProdA, gProdTh, gdgY, gdgA, gdgTh, driftY, driftA, driftTh, diffY, diffA, diffTh, itoCorr, itoCorrY, itoCorrTh, fStrat, fStratY, fStratTh, colCorrY, colCorrA, colCorrTh, Fin.sum_univ_two, Fin.sum_univ_one, Fin.isValue, Matrix.cons_val_zero, Matrix.cons_val_one, Matrix.cons_val_fin_one, Matrix.head_cons] <;> ring

theorem adj_gp_s_diagonal_22_en_unused_param_zero (f0 : K → K → K → K → K) (f0_d1 : K → K → K → K → K) (f0_d2 : K → K → K → K → K) (f0_d3 : K → K → K → K → K) (f1 : K → K → K → K → K) (f1_d1 : K → K → K → K → K) (f1_d2 : K → K → K → K → K) (f1_d3 : K → K → K → K → K) (g0 : K → K → K → K) (g0_d1 : K → K → K → K) (g0_d11 : K → K → K → K) (g0_d12 : K → K → K → K) (g0_d2 : K → K → K → K) (g1 : K → K → K → K) (g1_d1 : K → K → K → K) (g1_d11 : K → K → K → K) (g1_d12 : K → K → K → K) (g1_d2 : K → K → K → K) (t y0 y1 a0 a1 b bu th thu v0 v1 : K) :
    Gen.adj_gp_s_diagonal_22_en_out_0_5 g0 g0_d1 g0_d2 g1 g1_d1 g1_d2 t y0 y1 a0 a1 b bu th thu v0 v1 = 0 := by
  simp [Gen.adj_gp_s_diagonal_22_en_out_0_5]

theorem adj_gp_s_diagonal_22_en_graph (f0 : K → K → K → K → K) (f0_d1 : K → K → K → K → K) (f0_d2 : K → K → K → K → K) (f0_d3 : K → K → K → K → K) (f1 : K → K → K → K → K) (f1_d1 : K → K → K → K → K) (f1_d2 : K → K → K → K → K) (f1_d3 : K → K → K → K → K) (g0 : K → K → K → K) (g0_d1 : K → K → K → K) (g0_d11 : K → K → K → K) (g0_d12 : K → K → K → K) (g0_d2 : K → K → K → K) (g1 : K → K → K → K) (g1_d1 : K → K → K → K) (g1_d11 : K → K → K → K) (g1_d12 : K → K → K → K) (g1_d2 : K → K → K → K) (t y0 y1 a0 a1 b bu th thu v0 v1 : K) :
    Gen.adj_gp_s_diagonal_22_en_rg_out g0 g0_d1 g0_d2 g1 g1_d1 g1_d2 t y0 y1 a0 a1 b bu th thu v0 v1 = 1 ∧
    Gen.adj_gp_s_diagonal_22_en_leaf_out g0 g0_d1 g0_d2 g1 g1_d1 g1_d2 t y0 y1 a0 a1 b bu th thu v0 v1 = 0 ∧
    Gen.adj_gp_s_diagonal_22_en_rg_z_after g0 g0_d1 g0_d2 g1 g1_d1 g1_d2 t y0 y1 a0 a1 b bu th thu v0 v1 = 1 ∧
    Gen.adj_gp_s_diagonal_22_en_leaf_z_after g0 g0_d1 g0_d2 g1 g1_d1 g1_d2 t y0 y1 a0 a1 b bu th thu v0 v1 = 1 := by
  refine ⟨?_, ?_, ?_, ?_⟩ <;> simp only [Gen.adj_gp_s_diagonal_22_en_rg_out, Gen.adj_gp_s_diagonal_22_en_leaf_out, Gen.adj_gp_s_diagonal_22_en_rg_z_after, Gen.adj_gp_s_diagonal_22_en_leaf_z_after]

theorem adj_fgp_s_diagonal_22_ng_unused_param_zero (f0 : K → K → K → K → K) (f0_d1 : K → K → K → K → K) (f0_d2 : K → K → K → K → K) (f0_d3 : K → K → K → K → K) (f1 : K → K → K → K → K) (f1_d1 : K → K → K → K → K) (f1_d2 : K → K → K → K → K) (f1_d3 : K → K → K → K → K) (g0 : K → K → K → K) (g0_d1 : K → K → K → K) (g0_d11 : K → K → K → K) (g0_d12 : K → K → K → K) (g0_d2 : K → K → K → K) (g1 : K → K → K → K) (g1_d1 : K → K → K → K) (g1_d11 : K → K → K → K) (g1_d12 : K → K → K → K) (g1_d2 : K → K → K → K) (t y0 y1 a0 a1 b bu th thu v0 v1 : K) :
    Gen.adj_fgp_s_diagonal_22_ng_f_0_5 f0 f0_d1 f0_d2 f0_d3 f1 f1_d1 f1_d2 f1_d3 g0 g0_d1 g0_d2 g1 g1_d1 g1_d2 t y0 y1 a0 a1 b bu th thu v0 v1 = 0 ∧
    Gen.adj_fgp_s_diagonal_22_ng_gp_0_5 f0 f0_d1 f0_d2 f0_d3 f1 f1_d1 f1_d2 f1_d3 g0 g0_d1 g0_d2 g1 g1_d1 g1_d2 t y0 y1 a0 a1 b bu th thu v0 v1 = 0 := by
  refine ⟨?_, ?_⟩ <;> simp [Gen.adj_fgp_s_diagonal_22_ng_f_0_5, Gen.adj_fgp_s_diagonal_22_ng_gp_0_5]

theorem adj_fgp_s_diagonal_22_ng_pair (f0 : K → K → K → K → K) (f0_d1 : K → K → K → K → K) (f0_d2 : K → K → K → K → K) (f0_d3 : K → K → K → K → K) (f1 : K → K → K → K → K) (f1_d1 : K → K → K → K → K) (f1_d2 : K → K → K → K → K) (f1_d3 : K → K → K → K → K) (g0 : K → K → K → K) (g0_d1 : K → K → K → K) (g0_d11 : K → K → K → K) (g0_d12 : K → K → K → K) (g0_d2 : K → K → K → K) (g1 : K → K → K → K) (g1_d1 : K → K → K → K) (g1_d11 : K → K → K → K) (g1_d12 : K → K → K → K) (g1_d2 : K → K → K → K) (t y0 y1 a0 a1 b bu th thu v0 v1 : K) :
    Gen.adj_fgp_s_diagonal_22_ng_f_0_0 f0 f0_d1 f0_d2 f0_d3 f1 f1_d1 f1_d2 f1_d3 g0 g0_d1 g0_d2 g1 g1_d1 g1_d2 t y0 y1 a0 a1 b bu th thu v0 v1
      = Gen.adj_f_s_diagonal_22_ng_out_0_0 f0 f0_d1 f0_d2 f0_d3 f1 f1_d1 f1_d2 f1_d3 t y0 y1 a0 a1 b bu th thu ∧
    Gen.adj_fgp_s_diagonal_22_ng_f_0_1 f0 f0_d1 f0_d2 f0_d3 f1 f1_d1 f1_d2 f1_d3 g0 g0_d1 g0_d2 g1 g1_d1 g1_d2 t y0 y1 a0 a1 b bu th thu v0 v1
      = Gen.adj_f_s_diagonal_22_ng_out_0_1 f0 f0_d1 f0_d2 f0_d3 f1 f1_d1 f1_d2 f1_d3 t y0 y1 a0 a1 b bu th thu ∧
    Gen.adj_fgp_s_diagonal_22_ng_f_0_2 f0 f0_d1 f0_d2 f0_d3 f1 f1_d1 f1_d2 f1_d3 g0 g0_d1 g0_d2 g1 g1_d1 g1_d2 t y0 y1 a0 a1 b bu th thu v0 v1
      = Gen.adj_f_s_diagonal_22_ng_out_0_2 f0 f0_d1 f0_d2 f0_d3 f1 f1_d1 f1_d2 f1_d3 t y0 y1 a0 a1 b bu th thu ∧
    Gen.adj_fgp_s_diagonal_22_ng_f_0_3 f0 f0_d1 f0_d2 f0_d3 f1 f1_d1 f1_d2 f1_d3 g0 g0_d1 g0_d2 g1 g1_d1 g1_d2 t y0 y1 a0 a1 b bu th thu v0 v1
      = Gen.adj_f_s_diagonal_22_ng_out_0_3 f0 f0_d1 f0_d2 f0_d3 f1 f1_d1 f1_d2 f1_d3 t y0 y1 a0 a1 b bu th thu ∧
    Gen.adj_fgp_s_diagonal_22_ng_f_0_4 f0 f0_d1 f0_d2 f0_d3 f1 f1_d1 f1_d2 f1_d3 g0 g0_d1 g0_d2 g1 g1_d1 g1_d2 t y0 y1 a0 a1 b bu th thu v0 v1
      = Gen.adj_f_s_diagonal_22_ng_out_0_4 f0 f0_d1 f0_d2 f0_d3 f1 f1_d1 f1_d2 f1_d3 t y0 y1 a0 a1 b bu th thu ∧
    Gen.adj_fgp_s_diagonal_22_ng_f_0_5 f0 f0_d1 f0_d2 f0_d3 f1 f1_d1 f1_d2 f1_d3 g0 g0_d1 g0_d2 g1 g1_d1 g1_d2 t y0 y1 a0 a1 b bu th thu v0 v1
      = Gen.adj_f_s_diagonal_22_ng_out_0_5 f0 f0_d1 f0_d2 f0_d3 f1 f1_d1 f1_d2 f1_d3 t y0 y1 a0 a1 b bu th thu ∧
    Gen.adj_fgp_s_diagonal_22_ng_gp_0_0 f0 f0_d1 f0_d2 f0_d3 f1 f1_d1 f1_d2 f1_d3 g0 g0_d1 g0_d2 g1 g1_d1 g1_d2 t y0 y1 a0 a1 b bu th thu v0 v1
      = Gen.adj_gp_s_diagonal_22_ng_out_0_0 g0 g0_d1 g0_d2 g1 g1_d1 g1_d2 t y0 y1 a0 a1 b bu th thu v0 v1 ∧
    Gen.adj_fgp_s_diagonal_22_ng_gp_0_1 f0 f0_d1 f0_d2 f0_d3 f1 f1_d1 f1_d2 f1_d3 g0 g0_d1 g0_d2 g1 g1_d1 g1_d2 t y0 y1 a0 a1 b bu th thu v0 v1
      = Gen.adj_gp_s_diagonal_22_ng_out_0_1 g0 g0_d1 g0_d2 g1 g1_d1 g1_d2 t y0 y1 a0 a1 b bu th thu v0 v1 ∧
    Gen.adj_fgp_s_diagonal_22_ng_gp_0_2 f0 f0_d1 f0_d2 f0_d3 f1 f1_d1 f1_d2 f1_d3 g0 g0_d1 g0_d2 g1 g1_d1 g1_d2 t y0 y1 a0 a1 b bu th thu v0 v1
      = Gen.adj_gp_s_diagonal_22_ng_out_0_2 g0 g0_d1 g0_d2 g1 g1_d1 g1_d2 t y0 y1 a0 a1 b bu th thu v0 v1 ∧
    Gen.adj_fgp_s_diagonal_22_ng_gp_0_3 f0 f0_d1 f0_d2 f0_d3 f1 f1_d1 f1_d2 f1_d3 g0 g0_d1 g0_d2 g1 g1_d1 g1_d2 t y0 y1 a0 a1 b bu th thu v0 v1
      = Gen.adj_gp_s_diagonal_22_ng_out_0_3 g0 g0_d1 g0_d2 g1 g1_d1 g1_d2 t y0 y1 a0 a1 b bu th thu v0 v1 ∧
    Gen.adj_fgp_s_diagonal_22_ng_gp_0_4 f0 f0_d1 f0_d2 f0_d3 f1 f1_d1 f1_d2 f1_d3 g0 g0_d1 g0_d2 g1 g1_d1 g1_d2 t y0 y1 a0 a1 b bu th thu v0 v1
      = Gen.adj_gp_s_diagonal_22_ng_out_0_4 g0 g0_d1 g0_d2 g1 g1_d1 g1_d2 t y0 y1 a0 a1 b bu th thu v0 v1 ∧
    Gen.adj_fgp_s_diagonal_22_ng_gp_0_5 f0 f0_d1 f0_d2 f0_d3 f1 f1_d1 f1_d2 f1_d3 g0 g0_d1 g0_d2 g1 g1_d1 g1_d2 t y0 y1 a0 a1 b bu th thu v0 v1
      = Gen.adj_gp_s_diagonal_22_ng_out_0_5 g0 g0_d1 g0_d2 g1 g1_d1 g1_d2 t y0 y1 a0 a1 b bu th thu v0 v1 := by
  refine ⟨?_, ?_, ?_, ?_, ?_, ?_, ?_, ?_, ?_, ?_, ?_, ?_⟩ <;> simp only [Gen.adj_fgp_s_diagonal_22_ng_f_0_0, Gen.adj_f_s_diagonal_22_ng_out_0_0, Gen.adj_fgp_s_diagonal_22_ng_f_0_1, Gen.adj_f_s_diagonal_22_ng_out_0_1, Gen.adj_fgp_s_diagonal_22_ng_f_0_2, Gen.adj_f_s_diagonal_22_ng_out_0_2, Gen.adj_fgp_s_diagonal_22_ng_f_0_3, Gen.adj_f_s_diagonal_22_ng_out_0_3, Gen.adj_fgp_s_diagonal_22_ng_f_0_4, Gen.adj_f_s_diagonal_22_ng_out_0_4, Gen.adj_fgp_s_diagonal_22_ng_f_0_5, Gen.adj_f_s_diagonal_22_ng_out_0_5, Gen.adj_fgp_s_diagonal_22_ng_gp_0_0, Gen.adj_gp_s_diagonal_22_ng_out_0_0, Gen.adj_fgp_s_diagonal_22_ng_gp_0_1, Gen.adj_gp_s_diagonal_22_ng_out_0_1, Gen.adj_fgp_s_diagonal_22_ng_gp_0_2, Gen.adj_gp_s_diagonal_22_ng_out_0_2, Gen.adj_fgp_s_diagonal_22_ng_gp_0_3, Gen.adj_gp_s_diagonal_22_ng_out_0_3, Gen.adj_fgp_s_diagonal_22_ng_gp_0_4, Gen.adj_gp_s_diagonal_22_ng_out_0_4, Gen.adj_fgp_s_diagonal_22_ng_gp_0_5, Gen.adj_gp_s_diagonal_22_ng_out_0_5] <;> ring

theorem adj_fgp_s_diagonal_22_ng_graph (f0 : K → K → K → K → K) (f0_d1 : K → K → K → K → K) (f0_d2 : K → K → K → K → K) (f0_d3 : K → K → K → K → K) (f1 : K → K → K → K → K) (f1_d1 : K → K → K → K → K) (f1_d2 : K → K → K → K → K) (f1_d3 : K → K → K → K → K) (g0 : K → K → K → K) (g0_d1 : K → K → K → K) (g0_d11 : K → K → K → K) (g0_d12 : K → K → K → K) (g0_d2 : K → K → K → K) (g1 : K → K → K → K) (g1_d1 : K → K → K → K) (g1_d11 : K → K → K → K) (g1_d12 : K → K → K → K) (g1_d2 : K → K → K → K) (t y0 y1 a0 a1 b bu th thu v0 v1 : K) :
    Gen.adj_fgp_s_diagonal_22_ng_rg_f f0 f0_d1 f0_d2 f0_d3 f1 f1_d1 f1_d2 f1_d3 g0 g0_d1 g0_d2 g1 g1_d1 g1_d2 t y0 y1 a0 a1 b bu th thu v0 v1 = 0 ∧
    Gen.adj_fgp_s_diagonal_22_ng_leaf_f f0 f0_d1 f0_d2 f0_d3 f1 f1_d1 f1_d2 f1_d3 g0 g0_d1 g0_d2 g1 g1_d1 g1_d2 t y0 y1 a0 a1 b bu th thu v0 v1 = 1 ∧
    Gen.adj_fgp_s_diagonal_22_ng_rg_gp f0 f0_d1 f0_d2 f0_d3 f1 f1_d1 f1_d2 f1_d3 g0 g0_d1 g0_d2 g1 g1_d1 g1_d2 t y0 y1 a0 a1 b bu th thu v0 v1 = 0 ∧
    Gen.adj_fgp_s_diagonal_22_ng_leaf_gp f0 f0_d1 f0_d2 f0_d3 f1 f1_d1 f1_d2 f1_d3 g0 g0_d1 g0_d2 g1 g1_d1 g1_d2 t y0 y1 a0 a1 b bu th thu v0 v1 = 1 ∧
    Gen.adj_fgp_s_diagonal_22_ng_rg_z_after f0 f0_d1 f0_d2 f0_d3 f1 f1_d1 f1_d2 f1_d3 g0 g0_d1 g0_d2 g1 g1_d1 g1_d2 t y0 y1 a0 a1 b bu th thu v0 v1 = 0 ∧
    Gen.adj_fgp_s_diagonal_22_ng_leaf_z_after f0 f0_d1 f0_d2 f0_d3 f1 f1_d1 f1_d2 f1_d3 g0 g0_d1 g0_d2 g1 g1_d1 g1_d2 t y0 y1 a0 a1 b bu th thu v0 v1 = 1 := by
  refine ⟨?_, ?_, ?_, ?_, ?_, ?_⟩ <;> simp only [Gen.adj_fgp_s_diagonal_22_ng_rg_f, Gen.adj_fgp_s_diagonal_22_ng_leaf_f, Gen.adj_fgp_s_diagonal_22_ng_rg_gp, Gen.adj_fgp_s_diagonal_22_ng_leaf_gp, Gen.adj_fgp_s_diagonal_22_ng_rg_z_after, Gen.adj_fgp_s_diagonal_22_ng_leaf_z_after]

theorem adj_fgp_s_diagonal_22_en_unused_param_zero (f0 : K → K → K → K → K) (f0_d1 : K → K → K → K → K) (f0_d2 : K → K → K → K → K) (f0_d3 : K → K → K → K → K) (f1 : K → K → K → K → K) (f1_d1 : K → K → K → K → K) (f1_d2 : K → K → K → K → K) (f1_d3 : K → K → K → K → K) (g0 : K → K → K → K) (g0_d1 : K → K → K → K) (g0_d11 : K → K → K → K) (g0_d12 : K → K → K → K) (g0_d2 : K → K → K → K) (g1 : K → K → K → K) (g1_d1 : K → K → K → K) (g1_d11 : K → K → K → K) (g1_d12 : K → K → K → K) (g1_d2 : K → K → K → K) (t y0 y1 a0 a1 b bu th thu v0 v1 : K) :
    Gen.adj_fgp_s_diagonal_22_en_f_0_5 f0 f0_d1 f0_d2 f0_d3 f1 f1_d1 f1_d2 f1_d3 g0 g0_d1 g0_d2 g1 g1_d1 g1_d2 t y0 y1 a0 a1 b bu th thu v0 v1 = 0 ∧
    Gen.adj_fgp_s_diagonal_22_en_gp_0_5 f0 f0_d1 f0_d2 f0_d3 f1 f1_d1 f1_d2 f1_d3 g0 g0_d1 g0_d2 g1 g1_d1 g1_d2 t y0 y1 a0 a1 b bu th thu v0 v1 = 0 := by
  refine ⟨?_, ?_⟩ <;> simp [Gen.adj_fgp_s_diagonal_22_en_f_0_5, Gen.adj_fgp_s_diagonal_22_en_gp_0_5]

theorem adj_fgp_s_diagonal_22_en_pair (f0 : K → K → K → K → K) (f0_d1 : K → K → K → K → K) (f0_d2 : K → K → K → K → K) (f0_d3 : K → K → K → K → K) (f1 : K → K → K → K → K) (f1_d1 : K → K → K → K → K) (f1_d2 : K → K → K → K → K) (f1_d3 : K → K → K → K → K) (g0 : K → K → K → K) (g0_d1 : K → K → K → K) (g0_d11 : K → K → K → K) (g0_d12 : K → K → K → K) (g0_d2 : K → K → K → K) (g1 : K → K → K → K) (g1_d1 : K → K → K → K) (g1_d11 : K → K → K → K) (g1_d12 : K → K → K → K) (g1_d2 : K → K → K → K) (t y0 y1 a0 a1 b bu th thu v0 v1 : K) :
    Gen.adj_fgp_s_diagonal_22_en_f_0_0 f0 f0_d1 f0_d2 f0_d3 f1 f1_d1 f1_d2 f1_d3 g0 g0_d1 g0_d2 g1 g1_d1 g1_d2 t y0 y1 a0 a1 b bu th thu v0 v1
      = Gen.adj_f_s_diagonal_22_en_out_0_0 f0 f0_d1 f0_d2 f0_d3 f1 f1_d1 f1_d2 f1_d3 t y0 y1 a0 a1 b bu th thu ∧
    Gen.adj_fgp_s_diagonal_22_en_f_0_1 f0 f0_d1 f0_d2 f0_d3 f1 f1_d1 f1_d2 f1_d3 g0 g0_d1 g0_d2 g1 g1_d1 g1_d2 t y0 y1 a0 a1 b bu th thu v0 v1
      = Gen.adj_f_s_diagonal_22_en_out_0_1 f0 f0_d1 f0_d2 f0_d3 f1 f1_d1 f1_d2 f1_d3 t y0 y1 a0 a1 b bu th thu ∧
    Gen.adj_fgp_s_diagonal_22_en_f_0_2 f0 f0_d1 f0_d2 f0_d3 f1 f1_d1 f1_d2 f1_d3 g0 g0_d1 g0_d2 g1 g1_d1 g1_d2 t y0 y1 a0 a1 b bu th thu v0 v1
      = Gen.adj_f_s_diagonal_22_en_out_0_2 f0 f0_d1 f0_d2 f0_d3 f1 f1_d1 f1_d2 f1_d3 t y0 y1 a0 a1 b bu th thu ∧
    Gen.adj_fgp_s_diagonal_22_en_f_0_3 f0 f0_d1 f0_d2 f0_d3 f1 f1_d1 f1_d2 f1_d3 g0 g0_d1 g0_d2 g1 g1_d1 g1_d2 t y0 y1 a0 a1 b bu th thu v0 v1
      = Gen.adj_f_s_diagonal_22_en_out_0_3 f0 f0_d1 f0_d2 f0_d3 f1 f1_d1 f1_d2 f1_d3 t y0 y1 a0 a1 b bu th thu ∧
    Gen.adj_fgp_s_diagonal_22_en_f_0_4 f0 f0_d1 f0_d2 f0_d3 f1 f1_d1 f1_d2 f1_d3 g0 g0_d1 g0_d2 g1 g1_d1 g1_d2 t y0 y1 a0 a1 b bu th thu v0 v1
      = Gen.adj_f_s_diagonal_22_en_out_0_4 f0 f0_d1 f0_d2 f0_d3 f1 f1_d1 f1_d2 f1_d3 t y0 y1 a0 a1 b bu th thu ∧
    Gen.adj_fgp_s_diagonal_22_en_f_0_5 f0 f0_d1 f0_d2 f0_d3 f1 f1_d1 f1_d2 f1_d3 g0 g0_d1 g0_d2 g1 g1_d1 g1_d2 t y0 y1 a0 a1 b bu th thu v0 v1
      = Gen.adj_f_s_diagonal_22_en_out_0_5 f0 f0_d1 f0_d2 f0_d3 f1 f1_d1 f1_d2 f1_d3 t y0 y1 a0 a1 b bu th thu ∧
    Gen.adj_fgp_s_diagonal_22_en_gp_0_0 f0 f0_d1 f0_d2 f0_d3 f1 f1_d1 f1_d2 f1_d3 g0 g0_d1 g0_d2 g1 g1_d1 g1_d2 t y0 y1 a0 a1 b bu th thu v0 v1
      = Gen.adj_gp_s_diagonal_22_en_out_0_0 g0 g0_d1 g0_d2 g1 g1_d1 g1_d2 t y0 y1 a0 a1 b bu th thu v0 v1 ∧
    Gen.adj_fgp_s_diagonal_22_en_gp_0_1 f0 f0_d1 f0_d2 f0_d3 f1 f1_d1 f1_d2 f1_d3 g0 g0_d1 g0_d2 g1 g1_d1 g1_d2 t y0 y1 a0 a1 b bu th thu v0 v1
      = Gen.adj_gp_s_diagonal_22_en_out_0_1 g0 g0_d1 g0_d2 g1 g1_d1 g1_d2 t y0 y1 a0 a1 b bu th thu v0 v1 ∧
    Gen.adj_fgp_s_diagonal_22_en_gp_0_2 f0 f0_d1 f0_d2 f0_d3 f1 f1_d1 f1_d2 f1_d3 g0 g0_d1 g0_d2 g1 g1_d1 g1_d2 t y0 y1 a0 a1 b bu th thu v0 v1
      = Gen.adj_gp_s_diagonal_22_en_out_0_2 g0 g0_d1 g0_d2 g1 g1_d1 g1_d2 t y0 y1 a0 a1 b bu th thu v0 v1 ∧
    Gen.adj_fgp_s_diagonal_22_en_gp_0_3 f0 f0_d1 f0_d2 f0_d3 f1 f1_d1 f1_d2 f1_d3 g0 g0_d1 g0_d2 g1 g1_d1 g1_d2 t y0 y1 a0 a1 b bu th thu v0 v1
      = Gen.adj_gp_s_diagonal_22_en_out_0_3 g0 g0_d1 g0_d2 g1 g1_d1 g1_d2 t y0 y1 a0 a1 b bu th thu v0 v1 ∧
    Gen.adj_fgp_s_diagonal_22_en_gp_0_4 f0 f0_d1 f0_d2 f0_d3 f1 f1_d1 f1_d2 f1_d3 g0 g0_d1 g0_d2 g1 g1_d1 g1_d2 t y0 y1 a0 a1 b bu th thu v0 v1
      = Gen.adj_gp_s_diagonal_22_en_out_0_4 g0 g0_d1 g0_d2 g1 g1_d1 g1_d2 t y0 y1 a0 a1 b bu th thu v0 v1 ∧
    Gen.adj_fgp_s_diagonal_22_en_gp_0_5 f0 f0_d1 f0_d2 f0_d3 f1 f1_d1 f1_d2 f1_d3 g0 g0_d1 g0_d2 g1 g1_d1 g1_d2 t y0 y1 a0 a1 b bu th thu v0 v1
      = Gen.adj_gp_s_diagonal_22_en_out_0_5 g0 g0_d1 g0_d2 g1 g1_d1 g1_d2 t y0 y1 a0 a1 b bu th thu v0 v1 := by
  refine ⟨?_, ?_, ?_, ?_, ?_, ?_, ?_, ?_, ?_, ?_, ?_, ?_⟩ <;> simp only [Gen.adj_fgp_s_diagonal_22_en_f_0_0, Gen.adj_f_s_diagonal_22_en_out_0_0, Gen.adj_fgp_s_diagonal_22_en_f_0_1, Gen.adj_f_s_diagonal_22_en_out_0_1, Gen.adj_fgp_s_diagonal_22_en_f_0_2, Gen.adj_f_s_diagonal_22_en_out_0_2, Gen.adj_fgp_s_diagonal_22_en_f_0_3, Gen.adj_f_s_diagonal_22_en_out_0_3, Gen.adj_fgp_s_diagonal_22_en_f_0_4, Gen.adj_f_s_diagonal_22_en_out_0_4, Gen.adj_fgp_s_diagonal_22_en_f_0_5, Gen.adj_f_s_diagonal_22_en_out_0_5, Gen.adj_fgp_s_diagonal_22_en_gp_0_0, Gen.adj_gp_s_diagonal_22_en_out_0_0, Gen.adj_fgp_s_diagonal_22_en_gp_0_1, Gen.adj_gp_s_diagonal_22_en_out_0_1, Gen.adj_fgp_s_diagonal_22_en_gp_0_2, Gen.adj_gp_s_diagonal_22_en_out_0_2, Gen.adj_fgp_s_diagonal_22_en_gp_0_3, Gen.adj_gp_s_diagonal_22_en_out_0_3, Gen.adj_fgp_s_diagonal_22_en_gp_0_4, Gen.adj_gp_s_diagonal_22_en_out_0_4, Gen.adj_fgp_s_diagonal_22_en_gp_0_5, Gen.adj_gp_s_diagonal_22_en_out_0_5] <;> ring

theorem adj_fgp_s_diagonal_22_en_graph (f0 : K → K → K → K → K) (f0_d1 : K → K → K → K → K) (f0_d2 : K → K → K → K → K) (f0_d3 : K → K → K → K → K) (f1 : K → K → K → K → K) (f1_d1 : K → K → K → K → K) (f1_d2 : K → K → K → K → K) (f1_d3 : K → K → K → K → K) (g0 : K → K → K → K) (g0_d1 : K → K → K → K) (g0_d11 : K → K → K → K) (g0_d12 : K → K → K → K) (g0_d2 : K → K → K → K) (g1 : K → K → K → K) (g1_d1 : K → K → K → K) (g1_d11 : K → K → K → K) (g1_d12 : K → K → K → K) (g1_d2 : K → K → K → K) (t y0 y1 a0 a1 b bu th thu v0 v1 : K) :
    Gen.adj_fgp_s_diagonal_22_en_rg_f f0 f0_d1 f0_d2 f0_d3 f1 f1_d1 f1_d2 f1_d3 g0 g0_d1 g0_d2 g1 g1_d1 g1_d2 t y0 y1 a0 a1 b bu th thu v0 v1 = 1 ∧
    Gen.adj_fgp_s_diagonal_22_en_leaf_f f0 f0_d1 f0_d2 f0_d3 f1 f1_d1 f1_d2 f1_d3 g0 g0_d1 g0_d2 g1 g1_d1 g1_d2 t y0 y1 a0 a1 b bu th thu v0 v1 = 0 ∧
    Gen.adj_fgp_s_diagonal_22_en_rg_gp f0 f0_d1 f0_d2 f0_d3 f1 f1_d1 f1_d2 f1_d3 g0 g0_d1 g0_d2 g1 g1_d1 g1_d2 t y0 y1 a0 a1 b bu th thu v0 v1 = 1 ∧
    Gen.adj_fgp_s_diagonal_22_en_leaf_gp f0 f0_d1 f0_d2 f0_d3 f1 f1_d1 f1_d2 f1_d3 g0 g0_d1 g0_d2 g1 g1_d1 g1_d2 t y0 y1 a0 a1 b bu th thu v0 v1 = 0 ∧
    Gen.adj_fgp_s_diagonal_22_en_rg_z_after f0 f0_d1 f0_d2 f0_d3 f1 f1_d1 f1_d2 f1_d3 g0 g0_d1 g0_d2 g1 g1_d1 g1_d2 t y0 y1 a0 a1 b bu th thu v0 v1 = 1 ∧
    Gen.adj_fgp_s_diagonal_22_en_leaf_z_after f0 f0_d1 f0_d2 f0_d3 f1 f1_d1 f1_d2 f1_d3 g0 g0_d1 g0_d2 g1 g1_d1 g1_d2 t y0 y1 a0 a1 b bu th thu v0 v1 = 1 := by
  refine ⟨?_, ?_, ?_, ?_, ?_, ?_⟩ <;> simp only [Gen.adj_fgp_s_diagonal_22_en_rg_f, Gen.adj_fgp_s_diagonal_22_en_leaf_f, Gen.adj_fgp_s_diagonal_22_en_rg_gp, Gen.adj_fgp_s_diagonal_22_en_leaf_gp, Gen.adj_fgp_s_diagonal_22_en_rg_z_after, Gen.adj_fgp_s_diagonal_22_en_leaf_z_after]

theorem adj_gdg_s_diagonal_22_ng_spec (f0 : K → K → K → K → K) (f0_d1 : K → K → K → K → K) (f0_d2 : K → K → K → K → K) (f0_d3 : K → K → K → K → K) (f1 : K → K → K → K → K) (f1_d1 : K → K → K → K → K) (f1_d2 : K → K → K → K → K) (f1_d3 : K → K → K → K → K) (g0 : K → K → K → K) (g0_d1 : K → K → K → K) (g0_d11 : K → K → K → K) (g0_d12 : K → K → K → K) (g0_d2 : K → K → K → K) (g1 : K → K → K → K) (g1_d1 : K → K → K → K) (g1_d11 : K → K → K → K) (g1_d12 : K → K → K → K) (g1_d2 : K → K → K → K) (t y0 y1 a0 a1 b bu th thu w0 w1 v0 v1 : K) :
    Gen.adj_gdg_s_diagonal_22_ng_gp_0_0 g0 g0_d1 g0_d11 g0_d12 g0_d2 g1 g1_d1 g1_d11 g1_d12 g1_d2 t y0 y1 a0 a1 b bu th thu w0 w1 v0 v1
      = gProdY (jet_diagonal_22 f0 f0_d1 f0_d2 f0_d3 f1 f1_d1 f1_d2 f1_d3 g0 g0_d1 g0_d11 g0_d12 g0_d2 g1 g1_d1 g1_d11 g1_d12 g1_d2 t y0 y1 th) ![w0, w1] 0 ∧
    Gen.adj_gdg_s_diagonal_22_ng_gp_0_1 g0 g0_d1 g0_d11 g0_d12 g0_d2 g1 g1_d1 g1_d11 g1_d12 g1_d2 t y0 y1 a0 a1 b bu th thu w0 w1 v0 v1
      = gProdY (jet_diagonal_22 f0 f0_d1 f0_d2 f0_d3 f1 f1_d1 f1_d2 f1_d3 g0 g0_d1 g0_d11 g0_d12 g0_d2 g1 g1_d1 g1_d11 g1_d12 g1_d2 t y0 y1 th) ![w0, w1] 1 ∧
    Gen.adj_gdg_s_diagonal_22_ng_gp_0_2 g0 g0_d1 g0_d11 g0_d12 g0_d2 g1 g1_d1 g1_d11 g1_d12 g1_d2 t y0 y1 a0 a1 b bu th thu w0 w1 v0 v1
      = gProdA (jet_diagonal_22 f0 f0_d1 f0_d2 f0_d3 f1 f1_d1 f1_d2 f1_d3 g0 g0_d1 g0_d11 g0_d12 g0_d2 g1 g1_d1 g1_d11 g1_d12 g1_d2 t y0 y1 th) ![a0, a1] ![w0, w1] 0 ∧
    Gen.adj_gdg_s_diagonal_22_ng_gp_0_3 g0 g0_d1 g0_d11 g0_d12 g0_d2 g1 g1_d1 g1_d11 g1_d12 g1_d2 t y0 y1 a0 a1 b bu th thu w0 w1 v0 v1
      = gProdA (jet_diagonal_22 f0 f0_d1 f0_d2 f0_d3 f1 f1_d1 f1_d2 f1_d3 g0 g0_d1 g0_d11 g0_d12 g0_d2 g1 g1_d1 g1_d11 g1_d12 g1_d2 t y0 y1 th) ![a0, a1] ![w0, w1] 1 ∧
    Gen.adj_gdg_s_diagonal_22_ng_gp_0_4 g0 g0_d1 g0_d11 g0_d12 g0_d2 g1 g1_d1 g1_d11 g1_d12 g1_d2 t y0 y1 a0 a1 b bu th thu w0 w1 v0 v1
      = gProdTh (jet_diagonal_22 f0 f0_d1 f0_d2 f0_d3 f1 f1_d1 f1_d2 f1_d3 g0 g0_d1 g0_d11 g0_d12 g0_d2 g1 g1_d1 g1_d11 g1_d12 g1_d2 t y0 y1 th) ![a0, a1] ![w0, w1] 0 ∧
    Gen.adj_gdg_s_diagonal_22_ng_gp_0_5 g0 g0_d1 g0_d11 g0_d12 g0_d2 g1 g1_d1 g1_d11 g1_d12 g1_d2 t y0 y1 a0 a1 b bu th thu w0 w1 v0 v1
      = gProdTh (jet_diagonal_22 f0 f0_d1 f0_d2 f0_d3 f1 f1_d1 f1_d2 f1_d3 g0 g0_d1 g0_d11 g0_d12 g0_d2 g1 g1_d1 g1_d11 g1_d12 g1_d2 t y0 y1 th) ![a0, a1] ![w0, w1] 1 ∧
    Gen.adj_gdg_s_diagonal_22_ng_gdg_0_0 g0 g0_d1 g0_d11 g0_d12 g0_d2 g1 g1_d1 g1_d11 g1_d12 g1_d2 t y0 y1 a0 a1 b bu th thu w0 w1 v0 v1
      = gdgY (jet_diagonal_22 f0 f0_d1 f0_d2 f0_d3 f1 f1_d1 f1_d2 f1_d3 g0 g0_d1 g0_d11 g0_d12 g0_d2 g1 g1_d1 g1_d11 g1_d12 g1_d2 t y0 y1 th) ![v0, v1] 0 ∧
    Gen.adj_gdg_s_diagonal_22_ng_gdg_0_1 g0 g0_d1 g0_d11 g0_d12 g0_d2 g1 g1_d1 g1_d11 g1_d12 g1_d2 t y0 y1 a0 a1 b bu th thu w0 w1 v0 v1
      = gdgY (jet_diagonal_22 f0 f0_d1 f0_d2 f0_d3 f1 f1_d1 f1_d2 f1_d3 g0 g0_d1 g0_d11 g0_d12 g0_d2 g1 g1_d1 g1_d11 g1_d12 g1_d2 t y0 y1 th) ![v0, v1] 1 ∧
    Gen.adj_gdg_s_diagonal_22_ng_gdg_0_2 g0 g0_d1 g0_d11 g0_d12 g0_d2 g1 g1_d1 g1_d11 g1_d12 g1_d2 t y0 y1 a0 a1 b bu th thu w0 w1 v0 v1
      = gdgA (jet_diagonal_22 f0 f0_d1 f0_d2 f0_d3 f1 f1_d1 f1_d2 f1_d3 g0 g0_d1 g0_d11 g0_d12 g0_d2 g1 g1_d1 g1_d11 g1_d12 g1_d2 t y0 y1 th) ![a0, a1] ![v0, v1] 0 ∧
    Gen.adj_gdg_s_diagonal_22_ng_gdg_0_3 g0 g0_d1 g0_d11 g0_d12 g0_d2 g1 g1_d1 g1_d11 g1_d12 g1_d2 t y0 y1 a0 a1 b bu th thu w0 w1 v0 v1
      = gdgA (jet_diagonal_22 f0 f0_d1 f0_d2 f0_d3 f1 f1_d1 f1_d2 f1_d3 g0 g0_d1 g0_d11 g0_d12 g0_d2 g1 g1_d1 g1_d11 g1_d12 g1_d2 t y0 y1 th) ![a0, a1] ![v0, v1] 1 ∧
    Gen.adj_gdg_s_diagonal_22_ng_gdg_0_4 g0 g0_d1 g0_d11 g0_d12 g0_d2 g1 g1_d1 g1_d11 g1_d12 g1_d2 t y0 y1 a0 a1 b bu th thu w0 w1 v0 v1
      = gdgTh (jet_diagonal_22 f0 f0_d1 f0_d2 f0_d3 f1 f1_d1 f1_d2 f1_d3 g0 g0_d1 g0_d11 g0_d12 g0_d2 g1 g1_d1 g1_d11 g1_d12 g1_d2 t y0 y1 th) ![a0, a1] ![v0, v1] 0 ∧
    Gen.adj_gdg_s_diagonal_22_ng_gdg_0_5 g0 g0_d1 g0_d11 g0_d12 g0_d2 g1 g1_d1 g1_d11 g1_d12 g1_d2 t y0 y1 a0 a1 b bu th thu w0 w1 v0 v1
      = gdgTh (jet_diagonal_22 f0 f0_d1 f0_d2 f0_d3 f1 f1_d1 f1_d2 f1_d3 g0 g0_d1 g0_d11 g0_d12 g0_d2 g1 g1_d1 g1_d11 g1_d12 g1_d2 t y0 y1 th) ![a0, a1] ![v0, v1] 1 := by
  refine ⟨?_, ?_, ?_, ?_, ?_, ?_, ?_, ?_, ?_, ?_, ?_, ?_⟩ <;>
  simp [Gen.adj_gdg_s_diagonal_22_ng_gp_0_0, Gen.adj_gdg_s_diagonal_22_ng_gp_0_1, Gen.adj_gdg_s_diagonal_22_ng_gp_0_2, Gen.adj_gdg_s_diagonal_22_ng_gp_0_3, Gen.adj_gdg_s_diagonal_22_ng_gp_0_4, Gen.adj_gdg_s_diagonal_22_ng_gp_0_5, Gen.adj_gdg_s_diagonal_22_ng_gdg_0_0, Gen.adj_gdg_s_diagonal_22_ng_gdg_0_1, Gen.adj_gdg_s_diagonal_22_ng_gdg_0_2, Gen.adj_gdg_s_diagonal_22_ng_gdg_0_3, Gen.adj_gdg_s_diagonal_22_ng_gdg_0_4, Gen.adj_gdg_s_diagonal_22_ng_gdg_0_5, jet_diagonal_22, stratDriftY, stratDriftA, stratDriftTh, itoDriftY, itoDriftA, itoDriftTh, gProdY, gProdA, gProdTh, gdgY, gdgA, gdgTh, driftY, driftA, driftTh, diffY, diffA, diffTh, itoCorr, itoCorrY, itoCorrTh, fStrat, fStratY, fStratTh, colCorrY, colCorrA, colCorrTh, Fin.sum_univ_two, Fin.sum_univ_one, Fin.isValue, Matrix.cons_val_zero, Matrix.cons_val_one, Matrix.cons_val_fin_one, Matrix.head_cons] <;> ring

theorem adj_gdg_s_diagonal_22_ng_unused_param_zero (f0 : K → K → K → K → K) (f0_d1 : K → K → K → K → K) (f0_d2 : K → K → K → K → K) (f0_d3 : K → K → K → K → K) (f1 : K → K → K → K → K) (f1_d1 : K → K → K → K → K) (f1_d2 : K → K → K → K → K) (f1_d3 : K → K → K → K → K) (g0 : K → K → K → K) (g0_d1 : K → K → K → K) (g0_d11 : K → K → K → K) (g0_d12 : K → K → K → K) (g0_d2 : K → K → K → K) (g1 : K → K → K → K) (g1_d1 : K → K → K → K) (g1_d11 : K → K → K → K) (g1_d12 : K → K → K → K) (g1_d2 : K → K → K → K) (t y0 y1 a0 a1 b bu th thu w0 w1 v0 v1 : K) :
    Gen.adj_gdg_s_diagonal_22_ng_gp_0_5 g0 g0_d1 g0_d11 g0_d12 g0_d2 g1 g1_d1 g1_d11 g1_d12 g1_d2 t y0 y1 a0 a1 b bu th thu w0 w1 v0 v1 = 0 ∧
    Gen.adj_gdg_s_diagonal_22_ng_gdg_0_5 g0 g0_d1 g0_d11 g0_d12 g0_d2 g1 g1_d1 g1_d11 g1_d12 g1_d2 t y0 y1 a0 a1 b bu th thu w0 w1 v0 v1 = 0 := by
  refine ⟨?_, ?_⟩ <;> simp [Gen.adj_gdg_s_diagonal_22_ng_gp_0_5, Gen.adj_gdg_s_diagonal_22_ng_gdg_0_5]

theorem adj_gdg_s_diagonal_22_ng_pair (f0 : K → K → K → K → K) (f0_d1 : K → K → K → K → K) (f0_d2 : K → K → K → K → K) (f0_d3 : K → K → K → K → K) (f1 : K → K → K → K → K) (f1_d1 : K → K → K → K → K) (f1_d2 : K → K → K → K → K) (f1_d3 : K → K → K → K → K) (g0 : K → K → K → K) (g0_d1 : K → K → K → K) (g0_d11 : K → K → K → K) (g0_d12 : K → K → K → K) (g0_d2 : K → K → K → K) (g1 : K → K → K → K) (g1_d1 : K → K → K → K) (g1_d11 : K → K → K → K) (g1_d12 : K → K → K → K) (g1_d2 : K → K → K → K) (t y0 y1 a0 a1 b bu th thu w0 w1 v0 v1 : K) :
    Gen.adj_gdg_s_diagonal_22_ng_gp_0_0 g0 g0_d1 g0_d11 g0_d12 g0_d2 g1 g1_d1 g1_d11 g1_d12 g1_d2 t y0 y1 a0 a1 b bu th thu w0 w1 v0 v1
      = Gen.adj_gp_s_diagonal_22_ng_out_0_0 g0 g0_d1 g0_d2 g1 g1_d1 g1_d2 t y0 y1 a0 a1 b bu th thu w0 w1 ∧
    Gen.adj_gdg_s_diagonal_22_ng_gp_0_1 g0 g0_d1 g0_d11 g0_d12 g0_d2 g1 g1_d1 g1_d11 g1_d12 g1_d2 t y0 y1 a0 a1 b bu th thu w0 w1 v0 v1
      = Gen.adj_gp_s_diagonal_22_ng_out_0_1 g0 g0_d1 g0_d2 g1 g1_d1 g1_d2 t y0 y1 a0 a1 b bu th thu w0 w1 ∧
    Gen.adj_gdg_s_diagonal_22_ng_gp_0_2 g0 g0_d1 g0_d11 g0_d12 g0_d2 g1 g1_d1 g1_d11 g1_d12 g1_d2 t y0 y1 a0 a1 b bu th thu w0 w1 v0 v1
      = Gen.adj_gp_s_diagonal_22_ng_out_0_2 g0 g0_d1 g0_d2 g1 g1_d1 g1_d2 t y0 y1 a0 a1 b bu th thu w0 w1 ∧
    Gen.adj_gdg_s_diagonal_22_ng_gp_0_3 g0 g0_d1 g0_d11 g0_d12 g0_d2 g1 g1_d1 g1_d11 g1_d12 g1_d2 t y0 y1 a0 a1 b bu th thu w0 w1 v0 v1
      = Gen.adj_gp_s_diagonal_22_ng_out_0_3 g0 g0_d1 g0_d2 g1 g1_d1 g1_d2 t y0 y1 a0 a1 b bu th thu w0 w1 ∧
    Gen.adj_gdg_s_diagonal_22_ng_gp_0_4 g0 g0_d1 g0_d11 g0_d12 g0_d2 g1 g1_d1 g1_d11 g1_d12 g1_d2 t y0 y1 a0 a1 b bu th thu w0 w1 v0 v1
      = Gen.adj_gp_s_diagonal_22_ng_out_0_4 g0 g0_d1 g0_d2 g1 g1_d1 g1_d2 t y0 y1 a0 a1 b bu th thu w0 w1 ∧
    Gen.adj_gdg_s_diagonal_22_ng_gp_0_5 g0 g0_d1 g0_d11 g0_d12 g0_d2 g1 g1_d1 g1_d11 g1_d12 g1_d2 t y0 y1 a0 a1 b bu th thu w0 w1 v0 v1
      = Gen.adj_gp_s_diagonal_22_ng_out_0_5 g0 g0_d1 g0_d2 g1 g1_d1 g1_d2 t y0 y1 a0 a1 b bu th thu w0 w1 := by
  refine ⟨?_, ?_, ?_, ?_, ?_, ?_⟩ <;> simp only [Gen.adj_gdg_s_diagonal_22_ng_gp_0_0, Gen.adj_gp_s_diagonal_22_ng_out_0_0, Gen.adj_gdg_s_diagonal_22_ng_gp_0_1, Gen.adj_gp_s_diagonal_22_ng_out_0_1, Gen.adj_gdg_s_diagonal_22_ng_gp_0_2, Gen.adj_gp_s_diagonal_22_ng_out_0_2, Gen.adj_gdg_s_diagonal_22_ng_gp_0_3, Gen.adj_gp_s_diagonal_22_ng_out_0_3, Gen.adj_gdg_s_diagonal_22_ng_gp_0_4, Gen.adj_gp_s_diagonal_22_ng_out_0_4, Gen.adj_gdg_s_diagonal_22_ng_gp_0_5, Gen.adj_gp_s_diagonal_22_ng_out_0_5] <;> ring

theorem adj_gdg_s_diagonal_22_ng_graph (f0 : K → K → K → K → K) (f0_d1 : K → K → K → K → K) (f0_d2 : K → K → K → K → K) (f0_d3 : K → K → K → K → K) (f1 : K → K → K → K → K) (f1_d1 : K → K → K → K → K) (f1_d2 : K → K → K → K → K) (f1_d3 : K → K → K → K → K) (g0 : K → K → K → K) (g0_d1 : K → K → K → K) (g0_d11 : K → K → K → K) (g0_d12 : K → K → K → K) (g0_d2 : K → K → K → K) (g1 : K → K → K → K) (g1_d1 : K → K → K → K) (g1_d11 : K → K → K → K) (g1_d12 : K → K → K → K) (g1_d2 : K → K → K → K) (t y0 y1 a0 a1 b bu th thu w0 w1 v0 v1 : K) :
    Gen.adj_gdg_s_diagonal_22_ng_rg_gp g0 g0_d1 g0_d11 g0_d12 g0_d2 g1 g1_d1 g1_d11 g1_d12 g1_d2 t y0 y1 a0 a1 b bu th thu w0 w1 v0 v1 = 0 ∧
    Gen.adj_gdg_s_diagonal_22_ng_leaf_gp g0 g0_d1 g0_d11 g0_d12 g0_d2 g1 g1_d1 g1_d11 g1_d12 g1_d2 t y0 y1 a0 a1 b bu th thu w0 w1 v0 v1 = 1 ∧
    Gen.adj_gdg_s_diagonal_22_ng_rg_gdg g0 g0_d1 g0_d11 g0_d12 g0_d2 g1 g1_d1 g1_d11 g1_d12 g1_d2 t y0 y1 a0 a1 b bu th thu w0 w1 v0 v1 = 0 ∧
    Gen.adj_gdg_s_diagonal_22_ng_leaf_gdg g0 g0_d1 g0_d11 g0_d12 g0_d2 g1 g1_d1 g1_d11 g1_d12 g1_d2 t y0 y1 a0 a1 b bu th thu w0 w1 v0 v1 = 1 ∧
    Gen.adj_gdg_s_diagonal_22_ng_rg_z_after g0 g0_d1 g0_d11 g0_d12 g0_d2 g1 g1_d1 g1_d11 g1_d12 g1_d2 t y0 y1 a0 a1 b bu th thu w0 w1 v0 v1 = 0 ∧
    Gen.adj_gdg_s_diagonal_22_ng_leaf_z_after g0 g0_d1 g0_d11 g0_d12 g0_d2 g1 g1_d1 g1_d11 g1_d12 g1_d2 t y0 y1 a0 a1 b bu th thu w0 w1 v0 v1 = 1 := by
  refine ⟨?_, ?_, ?_, ?_, ?_, ?_⟩ <;> simp only [Gen.adj_gdg_s_diagonal_22_ng_rg_gp, Gen.adj_gdg_s_diagonal_22_ng_leaf_gp, Gen.adj_gdg_s_diagonal_22_ng_rg_gdg, Gen.adj_gdg_s_diagonal_22_ng_leaf_gdg, Gen.adj_gdg_s_diagonal_22_ng_rg_z_after, Gen.adj_gdg_s_diagonal_22_ng_leaf_z_after]

theorem adj_gdg_s_diagonal_22_en_spec (f0 : K → K → K → K → K) (f0_d1 : K → K → K → K → K) (f0_d2 : K → K → K → K → K) (f0_d3 : K → K → K → K → K) (f1 : K → K → K → K → K) (f1_d1 : K → K → K → K → K) (f1_d2 : K → K → K → K → K) (f1_d3 : K → K → K → K → K) (g0 : K → K → K → K) (g0_d1 : K → K → K → K) (g0_d11 : K → K → K → K) (g0_d12 : K → K → K → K) (g0_d2 : K → K → K → K) (g1 : K → K → K → K) (g1_d1 : K → K → K → K) (g1_d11 : K → K → K → K) (g1_d12 : K → K → K → K) (g1_d2 : K → K → K → K) (t y0 y1 a0 a1 b bu th thu w0 w1 v0 v1 : K) :
    Gen.adj_gdg_s_diagonal_22_en_gp_0_0 g0 g0_d1 g0_d11 g0_d12 g0_d2 g1 g1_d1 g1_d11 g1_d12 g1_d2 t y0 y1 a0 a1 b bu th thu w0 w1 v0 v1
      = gProdY (jet_diagonal_22 f0 f0_d1 f0_d2 f0_d3 f1 f1_d1 f1_d2 f1_d3 g0 g0_d1 g0_d11 g0_d12 g0_d2 g1 g1_d1 g1_d11 g1_d12 g1_d2 t y0 y1 th) ![w0, w1] 0 ∧
    Gen.adj_gdg_s_diagonal_22_en_gp_0_1 g0 g0_d1 g0_d11 g0_d12 g0_d2 g1 g1_d1 g1_d11 g1_d12 g1_d2 t y0 y1 a0 a1 b bu th thu w0 w1 v0 v1
      = gProdY (jet_diagonal_22 f0 f0_d1 f0_d2 f0_d3 f1 f1_d1 f1_d2 f1_d3 g0 g0_d1 g0_d11 g0_d12 g0_d2 g1 g1_d1 g1_d11 g1_d12 g1_d2 t y0 y1 th) ![w0, w1] 1 ∧
    Gen.adj_gdg_s_diagonal_22_en_gp_0_2 g0 g0_d1 g0_d11 g0_d12 g0_d2 g1 g1_d1 g1_d11 g1_d12 g1_d2 t y0 y1 a0 a1 b bu th thu w0 w1 v0 v1
      = gProdA (jet_diagonal_22 f0 f0_d1 f0_d2 f0_d3 f1 f1_d1 f1_d2 f1_d3 g0 g0_d1 g0_d11 g0_d12 g0_d2 g1 g1_d1 g1_d11 g1_d12 g1_d2 t y0 y1 th) ![a0, a1] ![w0, w1] 0 ∧
    Gen.adj_gdg_s_diagonal_22_en_gp_0_3 g0 g0_d1 g0_d11 g0_d12 g0_d2 g1 g1_d1 g1_d11 g1_d12 g1_d2 t y0 y1 a0 a1 b bu th thu w0 w1 v0 v1
      = gProdA (jet_diagonal_22 f0 f0_d1 f0_d2 f0_d3 f1 f1_d1 f1_d2 f1_d3 g0 g0_d1 g0_d11 g0_d12 g0_d2 g1 g1_d1 g1_d11 g1_d12 g1_d2 t y0 y1 th) ![a0, a1] ![w0, w1] 1 ∧
    Gen.adj_gdg_s_diagonal_22_en_gp_0_4 g0 g0_d1 g0_d11 g0_d12 g0_d2 g1 g1_d1 g1_d11 g1_d12 g1_d2 t y0 y1 a0 a1 b bu th thu w0 w1 v0 v1
      = gProdTh (jet_diagonal_22 f0 f0_d1 f0_d2 f0_d3 f1 f1_d1 f1_d2 f1_d3 g0 g0_d1 g0_d11 g0_d12 g0_d2 g1 g1_d1 g1_d11 g1_d12 g1_d2 t y0 y1 th) ![a0, a1] ![w0, w1] 0 ∧
    Gen.adj_gdg_s_diagonal_22_en_gp_0_5 g0 g0_d1 g0_d11 g0_d12 g0_d2 g1 g1_d1 g1_d11 g1_d12 g1_d2 t y0 y1 a0 a1 b bu th thu w0 w1 v0 v1
      = gProdTh (jet_diagonal_22 f0 f0_d1 f0_d2 f0_d3 f1 f1_d1 f1_d2 f1_d3 g0 g0_d1 g0_d11 g0_d12 g0_d2 g1 g1_d1 g1_d11 g1_d12 g1_d2 t y0 y1 th) ![a0, a1] ![w0, w1] 1 ∧
    Gen.adj_gdg_s_diagonal_22_en_gdg_0_0 g0 g0_d1 g0_d11 g0_d12 g0_d2 g1 g1_d1 g1_d11 g1_d12 g1_d2 t y0 y1 a0 a1 b bu th thu w0 w1 v0 v1
      = gdgY (jet_diagonal_22 f0 f0_d1 f0_d2 f0_d3 f1 f1_d1 f1_d2 f1_d3 g0 g0_d1 g0_d11 g0_d12 g0_d2 g1 g1_d1 g1_d11 g1_d12 g1_d2 t y0 y1 th) ![v0, v1] 0 ∧
    Gen.adj_gdg_s_diagonal_22_en_gdg_0_1 g0 g0_d1 g0_d11 g0_d12 g0_d2 g1 g1_d1 g1_d11 g1_d12 g1_d2 t y0 y1 a0 a1 b bu th thu w0 w1 v0 v1
      = gdgY (jet_diagonal_22 f0 f0_d1 f0_d2 f0_d3 f1 f1_d1 f1_d2 f1_d3 g0 g0_d1 g0_d11 g0_d12 g0_d2 g1 g1_d1 g1_d11 g1_d12 g1_d2 t y0 y1 th) ![v0, v1] 1 ∧
    Gen.adj_gdg_s_diagonal_22_en_gdg_0_2 g0 g0_d1 g0_d11 g0_d12 g0_d2 g1 g1_d1 g1_d11 g1_d12 g1_d2 t y0 y1 a0 a1 b bu th thu w0 w1 v0 v1
      = gdgA (jet_diagonal_22 f0 f0_d1 f0_d2 f0_d3 f1 f1_d1 f1_d2 f1_d3 g0 g0_d1 g0_d11 g0_d12 g0_d2 g1 g1_d1 g1_d11 g1_d12 g1_d2 t y0 y1 th) ![a0, a1] ![v0, v1] 0 ∧
    Gen.adj_gdg_s_diagonal_22_en_gdg_0_3 g0 g0_d1 g0_d11 g0_d12 g0_d2 g1 g1_d1 g1_d11 g1_d12 g1_d2 t y0 y1 a0 a1 b bu th thu w0 w1 v0 v1
      = gdgA (jet_diagonal_22 f0 f0_d1 f0_d2 f0_d3 f1 f1_d1 f1_d2 f1_d3 g0 g0_d1 g0_d11 g0_d12 g0_d2 g1 g1_d1 g1_d11 g1_d12 g1_d2 t y0 y1 th) ![a0, a1] ![v0, v1] 1 ∧
    Gen.adj_gdg_s_diagonal_22_en_gdg_0_4 g0 g0_d1 g0_d11 g0_d12 g0_d2 g1 g1_d1 g1_d11 g1_d12 g1_d2 t y0 y1 a0 a1 b bu th thu w0 w1 v0 v1
      = gdgTh (jet_diagonal_22 f0 f0_d1 f0_d2 f0_d3 f1 f1_d1 f1_d2 f1_d3 g0 g0_d1 g0_d11 g0_d12 g0_d2 g1 g1_d1 g1_d11 g1_d12 g1_d2 t y0 y1 th) ![a0, a1] ![v0, v1] 0 ∧
    Gen.adj_gdg_s_diagonal_22_en_gdg_0_5 g0 g0_d1 g0_d11 g0_d12 g0_d2 g1 g1_d1 g1_d11 g1_d12 g1_d2 t y0 y1 a0 a1 b bu th thu w0 w1 v0 v1
      = gdgTh (jet_diagonal_22 f0 f0_d1 f0_d2 f0_d3 f1 f1_d1 f1_d2 f1_d3 g0 g0_d1 g0_d11 g0_d12 g0_d2 g1 g1_d1 g1_d11 g1_d12 g1_d2 t y0 y1 th) ![a0, a1] ![v0, v1] 1 := by
  refine ⟨?_, ?_, ?_, ?_, ?_, ?_, ?_, ?_, ?_, ?_, ?_, ?_⟩ <;>
  simp [Gen.adj_gdg_s_diagonal_22_en_gp_0_0, Gen.adj_gdg_s_diagonal_22_en_gp_0_1, Gen.adj_gdg_s_diagonal_22_en_gp_0_2, Gen.adj_gdg_s_diagonal_22_en_gp_0_3, Gen.adj_gdg_s_diagonal_22_en_gp_0_4, Gen.adj_gdg_s_diagonal_22_en_gp_0_5, Gen.adj_gdg_s_diagonal_22_en_gdg_0_0, Gen.adj_gdg_s_diagonal_22_en_gdg_0_1, Gen.adj_gdg_s_diagonal_22_en_gdg_0_2, Gen.adj_gdg_s_diagonal_22_en_gdg_0_3, Gen.adj_gdg_s_diagonal_22_en_gdg_0_4, Gen.adj_gdg_s_diagonal_22_en_gdg_0_5, jet_diagonal_22, stratDriftY, stratDriftA, stratDriftTh, itoDriftY, itoDriftA, itoDriftTh, gProdY, gProdA, gProdTh, gdgY, gdgA, gdgTh, driftY, driftA, driftTh, diffY, diffA, diffTh, itoCorr, itoCorrY, itoCorrTh, fStrat, fStratY, fStratTh, colCorrY, colCorrA, colCorrTh, Fin.sum_univ_two, Fin.sum_univ_one, Fin.isValue, Matrix.cons_val_zero, Matrix.cons_val_one, Matrix.cons_val_fin_one, Matrix.head_cons] <;> ring

theorem adj_gdg_s_diagonal_22_en_unused_param_zero (f0 : K → K → K → K → K) (f0_d1 : K → K → K → K → K) (f0_d2 : K → K → K → K → K) (f0_d3 : K → K → K → K → K) (f1 : K → K → K → K → K) (f1_d1 : K → K → K → K → K) (f1_d2 : K → K → K → K → K) (f1_d3 : K → K → K → K → K) (g0 : K → K → K → K) (g0_d1 : K → K → K → K) (g0_d11 : K → K → K → K) (g0_d12 : K → K → K → K) (g0_d2 : K → K → K → K) (g1 : K → K → K → K) (g1_d1 : K → K → K → K) (g1_d11 : K → K → K → K) (g1_d12 : K → K → K → K) (g1_d2 : K → K → K → K) (t y0 y1 a0 a1 b bu th thu w0 w1 v0 v1 : K) :
    Gen.adj_gdg_s_diagonal_22_en_gp_0_5 g0 g0_d1 g0_d11 g0_d12 g0_d2 g1 g1_d1 g1_d11 g1_d12 g1_d2 t y0 y1 a0 a1 b bu th thu w0 w1 v0 v1 = 0 ∧
    Gen.adj_gdg_s_diagonal_22_en_gdg_0_5 g0 g0_d1 g0_d11 g0_d12 g0_d2 g1 g1_d1 g1_d11 g1_d12 g1_d2 t y0 y1 a0 a1 b bu th thu w0 w1 v0 v1 = 0 := by
  refine ⟨?_, ?_⟩ <;> simp [Gen.adj_gdg_s_diagonal_22_en_gp_0_5, Gen.adj_gdg_s_diagonal_22_en_gdg_0_5]

theorem adj_gdg_s_diagonal_22_en_pair (f0 : K → K → K → K → K) (f0_d1 : K → K → K → K → K) (f0_d2 : K → K → K → K → K) (f0_d3 : K → K → K → K → K) (f1 : K → K → K → K → K) (f1_d1 : K → K → K → K → K) (f1_d2 : K → K → K → K → K) (f1_d3 : K → K → K → K → K) (g0 : K → K → K → K) (g0_d1 : K → K → K → K) (g0_d11 : K → K → K → K) (g0_d12 : K → K → K → K) (g0_d2 : K → K → K → K) (g1 : K → K → K → K) (g1_d1 : K → K → K → K) (g1_d11 : K → K → K → K) (g1_d12 : K → K → K → K) (g1_d2 : K → K → K → K) (t y0 y1 a0 a1 b bu th thu w0 w1 v0 v1 : K) :
    Gen.adj_gdg_s_diagonal_22_en_gp_0_0 g0 g0_d1 g0_d11 g0_d12 g0_d2 g1 g1_d1 g1_d11 g1_d12 g1_d2 t y0 y1 a0 a1 b bu th thu w0 w1 v0 v1
      = Gen.adj_gp_s_diagonal_22_en_out_0_0 g0 g0_d1 g0_d2 g1 g1_d1 g1_d2 t y0 y1 a0 a1 b bu th thu w0 w1 ∧
    Gen.adj_gdg_s_diagonal_22_en_gp_0_1 g0 g0_d1 g0_d11 g0_d12 g0_d2 g1 g1_d1 g1_d11 g1_d12 g1_d2 t y0 y1 a0 a1 b bu th thu w0 w1 v0 v1
      = Gen.adj_gp_s_diagonal_22_en_out_0_1 g0 g0_d1 g0_d2 g1 g1_d1 g1_d2 t y0 y1 a0 a1 b bu th thu w0 w1 ∧
    Gen.adj_gdg_s_diagonal_22_en_gp_0_2 g0 g0_d1 g0_d11 g0_d12 g0_d2 g1 g1_d1 g1_d11 g1_d12 g1_d2 t y0 y1 a0 a1 b bu th thu w0 w1 v0 v1
      = Gen.adj_gp_s_diagonal_22_en_out_0_2 g0 g0_d1 g0_d2 g1 g1_d1 g1_d2 t y0 y1 a0 a1 b bu th thu w0 w1 ∧
    Gen.adj_gdg_s_diagonal_22_en_gp_0_3 g0 g0_d1 g0_d11 g0_d12 g0_d2 g1 g1_d1 g1_d11 g1_d12 g1_d2 t y0 y1 a0 a1 b bu th thu w0 w1 v0 v1
      = Gen.adj_gp_s_diagonal_22_en_out_0_3 g0 g0_d1 g0_d2 g1 g1_d1 g1_d2 t y0 y1 a0 a1 b bu th thu w0 w1 ∧
    Gen.adj_gdg_s_diagonal_22_en_gp_0_4 g0 g0_d1 g0_d11 g0_d12 g0_d2 g1 g1_d1 g1_d11 g1_d12 g1_d2 t y0 y1 a0 a1 b bu th thu w0 w1 v0 v1
      = Gen.adj_gp_s_diagonal_22_en_out_0_4 g0 g0_d1 g0_d2 g1 g1_d1 g1_d2 t y0 y1 a0 a1 b bu th thu w0 w1 ∧
    Gen.adj_gdg_s_diagonal_22_en_gp_0_5 g0 g0_d1 g0_d11 g0_d12 g0_d2 g1 g1_d1 g1_d11 g1_d12 g1_d2 t y0 y1 a0 a1 b bu th thu w0 w1 v0 v1
      = Gen.adj_gp_s_diagonal_22_en_out_0_5 g0 g0_d1 g0_d2 g1 g1_d1 g1_d2 t y0 y1 a0 a1 b bu th thu w0 w1 := by
  refine ⟨?_, ?_, ?_, ?_, ?_, ?_⟩ <;> simp only [Gen.adj_gdg_s_diagonal_22_en_gp_0_0, Gen.adj_gp_s_diagonal_22_en_out_0_0, Gen.adj_gdg_s_diagonal_22_en_gp_0_1, Gen.adj_gp_s_diagonal_22_en_out_0_1, Gen.adj_gdg_s_diagonal_22_en_gp_0_2, Gen.adj_gp_s_diagonal_22_en_out_0_2, Gen.adj_gdg_s_diagonal_22_en_gp_0_3, Gen.adj_gp_s_diagonal_22_en_out_0_3, Gen.adj_gdg_s_diagonal_22_en_gp_0_4, Gen.adj_gp_s_diagonal_22_en_out_0_4, Gen.adj_gdg_s_diagonal_22_en_gp_0_5, Gen.adj_gp_s_diagonal_22_en_out_0_5] <;> ring

theorem adj_gdg_s_diagonal_22_en_graph (f0 : K → K → K → K → K) (f0_d1 : K → K → K → K → K) (f0_d2 : K → K → K → K → K) (f0_d3 : K → K → K → K → K) (f1 : K → K → K → K → K) (f1_d1 : K → K → K → K → K) (f1_d2 : K → K → K → K → K) (f1_d3 : K → K → K → K → K) (g0 : K → K → K → K) (g0_d1 : K → K → K → K) (g0_d11 : K → K → K → K) (g0_d12 : K → K → K → K) (g0_d2 : K → K → K → K) (g1 : K → K → K → K) (g1_d1 : K → K → K → K) (g1_d11 : K → K → K → K) (g1_d12 : K → K → K → K) (g1_d2 : K → K → K → K) (t y0 y1 a0 a1 b bu th thu w0 w1 v0 v1 : K) :
    Gen.adj_gdg_s_diagonal_22_en_rg_gp g0 g0_d1 g0_d11 g0_d12 g0_d2 g1 g1_d1 g1_d11 g1_d12 g1_d2 t y0 y1 a0 a1 b bu th thu w0 w1 v0 v1 = 1 ∧
    Gen.adj_gdg_s_diagonal_22_en_leaf_gp g0 g0_d1 g0_d11 g0_d12 g0_d2 g1 g1_d1 g1_d11 g1_d12 g1_d2 t y0 y1 a0 a1 b bu th thu w0 w1 v0 v1 = 0 ∧
    Gen.adj_gdg_s_diagonal_22_en_rg_gdg g0 g0_d1 g0_d11 g0_d12 g0_d2 g1 g1_d1 g1_d11 g1_d12 g1_d2 t y0 y1 a0 a1 b bu th thu w0 w1 v0 v1 = 1 ∧
    Gen.adj_gdg_s_diagonal_22_en_leaf_gdg g0 g0_d1 g0_d11 g0_d12 g0_d2 g1 g1_d1 g1_d11 g1_d12 g1_d2 t y0 y1 a0 a1 b bu th thu w0 w1 v0 v1 = 0 ∧
    Gen.adj_gdg_s_diagonal_22_en_rg_z_after g0 g0_d1 g0_d11 g0_d12 g0_d2 g1 g1_d1 g1_d11 g1_d12 g1_d2 t y0 y1 a0 a1 b bu th thu w0 w1 v0 v1 = 1 ∧
    Gen.adj_gdg_s_diagonal_22_en_leaf_z_after g0 g0_d1 g0_d11 g0_d12 g0_d2 g1 g1_d1 g1_d11 g1_d12 g1_d2 t y0 y1 a0 a1 b bu th thu w0 w1 v0 v1 = 1 := by
  refine ⟨?_, ?_, ?_, ?_, ?_, ?_⟩ <;> simp only [Gen.adj_gdg_s_diagonal_22_en_rg_gp, Gen.adj_gdg_s_diagonal_22_en_leaf_gp, Gen.adj_gdg_s_diagonal_22_en_rg_gdg, Gen.adj_gdg_s_diagonal_22_en_leaf_gdg, Gen.adj_gdg_s_diagonal_22_en_rg_z_after, Gen.adj_gdg_s_diagonal_22_en_leaf_z_after]

theorem adj_f_s_additive_11_ng_spec (f : K → K → K → K) (f_d1 : K → K → K → K) (f_d2 : K → K → K → K) (g : K → K → K) (g_d1 : K → K → K) (t y0 a0 b bu th thu : K) :
    Gen.adj_f_s_additive_11_ng_out_0_0 f f_d1 f_d2 t y0 a0 b bu th thu
      = stratDriftY (jet_additive_11 f f_d1 f_d2 g g_d1 t y0 th) 0 ∧
    Gen.adj_f_s_additive_11_ng_out_0_1 f f_d1 f_d2 t y0 a0 b bu th thu
      = stratDriftA (jet_additive_11 f f_d1 f_d2 g g_d1 t y0 th) ![a0] 0 ∧
    Gen.adj_f_s_additive_11_ng_out_0_2 f f_d1 f_d2 t y0 a0 b bu th thu
      = stratDriftTh (jet_additive_11 f f_d1 f_d2 g g_d1 t y0 th) ![a0] 0 ∧
    Gen.adj_f_s_additive_11_ng_out_0_3 f f_d1 f_d2 t y0 a0 b bu th thu
      = stratDriftTh (jet_additive_11 f f_d1 f_d2 g g_d1 t y0 th) ![a0] 1 := by
  refine ⟨?_, ?_, ?_, ?_⟩ <;>
  simp [Gen.adj_f_s_additive_11_ng_out_0_0, Gen.adj_f_s_additive_11_ng_out_0_1, Gen.adj_f_s_additive_11_ng_out_0_2, Gen.adj_f_s_additive_11_ng_out_0_3, jet_additive_11, stratDriftY, stratDriftA, stratDriftTh, itoDriftY, itoDriftA, itoDriftTh, gProdY, gProdA, gProdTh, gdgY, gdgA, gdgTh, driftY, driftA, driftTh, diffY, diffA, diffTh, itoCorr, itoCorrY, itoCorrTh, fStrat, fStratY, fStratTh, colCorrY, colCorrA, colCorrTh, Fin.sum_univ_two, Fin.sum_univ_one, Fin.isValue, Matrix.cons_val_zero, Matrix.cons_val_one, Matrix.cons_val_fin_one, Matrix.head_cons] <;> ring

theorem adj_f_s_additive_11_ng_unused_param_zero (f : K → K → K → K) (f_d1 : K → K → K → K) (f_d2 : K → K → K → K) (g : K → K → K) (g_d1 : K → K → K) (t y0 a0 b bu th thu : K) :
    Gen.adj_f_s_additive_11_ng_out_0_3 f f_d1 f_d2 t y0 a0 b bu th thu = 0 := by
  simp [Gen.adj_f_s_additive_11_ng_out_0_3]

theorem adj_f_s_additive_11_ng_graph (f : K → K → K → K) (f_d1 : K → K → K → K) (f_d2 : K → K → K → K) (g : K → K → K) (g_d1 : K → K → K) (t y0 a0 b bu th thu : K) :
    Gen.adj_f_s_additive_11_ng_rg_out f f_d1 f_d2 t y0 a0 b bu th thu = 0 ∧
    Gen.adj_f_s_additive_11_ng_leaf_out f f_d1 f_d2 t y0 a0 b bu th thu = 1 ∧
    Gen.adj_f_s_additive_11_ng_rg_z_after f f_d1 f_d2 t y0 a0 b bu th thu = 0 ∧
    Gen.adj_f_s_additive_11_ng_leaf_z_after f f_d1 f_d2 t y0 a0 b bu th thu = 1 := by
  refine ⟨?_, ?_, ?_, ?_⟩ <;> simp only [Gen.adj_f_s_additive_11_ng_rg_out, Gen.adj_f_s_additive_11_ng_leaf_out, Gen.adj_f_s_additive_11_ng_rg_z_after, Gen.adj_f_s_additive_11_ng_leaf_z_after]

theorem adj_f_s_additive_11_en_spec (f : K → K → K → K) (f_d1 : K → K → K → K) (f_d11 : K → K → K → K) (f_d12 : K → K → K → K) (f_d2 : K → K → K → K) (f_d22 : K → K → K → K) (g : K → K → K) (g_d1 : K → K → K) (t y0 a0 b bu th thu : K) :
    Gen.adj_f_s_additive_11_en_out_0_0 f f_d1 f_d11 f_d12 f_d2 f_d22 t y0 a0 b bu th thu
      = stratDriftY (jet_additive_11 f f_d1 f_d2 g g_d1 t y0 th) 0 ∧
    Gen.adj_f_s_additive_11_en_out_0_1 f f_d1 f_d11 f_d12 f_d2 f_d22 t y0 a0 b bu th thu
      = stratDriftA (jet_additive_11 f f_d1 f_d2 g g_d1 t y0 th) ![a0] 0 ∧
    Gen.adj_f_s_additive_11_en_out_0_2 f f_d1 f_d11 f_d12 f_d2 f_d22 t y0 a0 b bu th thu
      = stratDriftTh (jet_additive_11 f f_d1 f_d2 g g_d1 t y0 th) ![a0] 0 ∧
    Gen.adj_f_s_additive_11_en_out_0_3 f f_d1 f_d11 f_d12 f_d2 f_d22 t y0 a0 b bu th thu
      = stratDriftTh (jet_additive_11 f f_d1 f_d2 g g_d1 t y0 th) ![a0] 1 := by
  refine ⟨?_, ?_, ?_, ?_⟩ <;>
  simp [Gen.adj_f_s_additive_11_en_out_0_0, Gen.adj_f_s_additive_11_en_out_0_1, Gen.adj_f_s_additive_11_en_out_0_2, Gen.adj_f_s_additive_11_en_out_0_3, jet_additive_11, stratDriftY, stratDriftA, stratDriftTh, itoDriftY, itoDriftA, itoDriftTh, gProdY, gProdA, gProdTh, gdgY, gdgA, gdgTh, driftY, driftA, driftTh, diffY, diffA, diffTh, itoCorr, itoCorrY, itoCorrTh, fStrat, fStratY, fStratTh, colCorrY, colCorrA, colCorrTh, Fin.sum_univ_two, Fin.sum_univ_one, Fin.isValue, Matrix.cons_val_zero, Matrix.cons_val_one, Matrix.cons_val_fin_one, Matrix.head_cons] <;> ring

theorem adj_f_s_additive_11_en_unused_param_zero (f : K → K → K → K) (f_d1 : K → K → K → K) (f_d11 : K → K → K → K) (f_d12 : K → K → K → K) (f_d2 : K → K → K → K) (f_d22 : K → K → K → K) (g : K → K → K) (g_d1 : K → K → K) (t y0 a0 b bu th thu : K) :
    Gen.adj_f_s_additive_11_en_out_0_3 f f_d1 f_d11 f_d12 f_d2 f_d22 t y0 a0 b bu th thu = 0 := by
  simp [Gen.adj_f_s_additive_11_en_out_0_3]

theorem adj_f_s_additive_11_en_graph (f : K → K → K → K) (f_d1 : K → K → K → K) (f_d11 : K → K → K → K) (f_d12 : K → K → K → K) (f_d2 : K → K → K → K) (f_d22 : K → K → K → K) (g : K → K → K) (g_d1 : K → K → K) (t y0 a0 b bu th thu : K) :
    Gen.adj_f_s_additive_11_en_rg_out f f_d1 f_d11 f_d12 f_d2 f_d22 t y0 a0 b bu th thu = 1 ∧
    Gen.adj_f_s_additive_11_en_leaf_out f f_d1 f_d11 f_d12 f_d2 f_d22 t y0 a0 b bu th thu = 0 ∧
    Gen.adj_f_s_additive_11_en_rg_z_after f f_d1 f_d11 f_d12 f_d2 f_d22 t y0 a0 b bu th thu = 1 ∧
    Gen.adj_f_s_additive_11_en_leaf_z_after f f_d1 f_d11 f_d12 f_d2 f_d22 t y0 a0 b bu th thu = 1 := by
  refine ⟨?_, ?_, ?_, ?_⟩ <;> simp only [Gen.adj_f_s_additive_11_en_rg_out, Gen.adj_f_s_additive_11_en_leaf_out, Gen.adj_f_s_additive_11_en_rg_z_after, Gen.adj_f_s_additive_11_en_leaf_z_after]

theorem adj_gp_s_additive_11_ng_spec (f : K → K → K → K) (f_d1 : K → K → K → K) (f_d2 : K → K → K → K) (g : K → K → K) (g_d1 : K → K → K) (t y0 a0 b bu th thu v0 : K) :
    Gen.adj_gp_s_additive_11_ng_out_0_0 g g_d1 t y0 a0 b bu th thu v0
      = gProdY (jet_additive_11 f f_d1 f_d2 g g_d1 t y0 th) ![v0] 0 ∧
    Gen.adj_gp_s_additive_11_ng_out_0_1 g g_d1 t y0 a0 b bu th thu v0
      = gProdA (jet_additive_11 f f_d1 f_d2 g g_d1 t y0 th) ![a0] ![v0] 0 ∧
    Gen.adj_gp_s_additive_11_ng_out_0_2 g g_d1 t y0 a0 b bu th thu v0
      = gProdTh (jet_additive_11 f f_d1 f_d2 g g_d1 t y0 th) ![a0] ![v0] 0 ∧
    Gen.adj_gp_s_additive_11_ng_out_0_3 g g_d1 t y0 a0 b bu th thu v0
      = gProdTh (jet_additive_11 f f_d1 f_d2 g g_d1 t y0 th) ![a0] ![v0] 1 := by
  refine ⟨?_, ?_, ?_, ?_⟩ <;>
  simp [Gen.adj_gp_s_additive_11_ng_out_0_0, Gen.adj_gp_s_additive_11_ng_out_0_1, Gen.adj_gp_s_additive_11_ng_out_0_2, Gen.adj_gp_s_additive_11_ng_out_0_3, jet_additive_11, stratDriftY, stratDriftA, stratDriftTh, itoDriftY, itoDriftA, itoDriftTh, gProdY, gProdA, gProdTh, gdgY, gdgA, gdgTh, driftY, driftA, driftTh, diffY, diffA, diffTh, itoCorr, itoCorrY, itoCorrTh, fStrat, fStratY, fStratTh, colCorrY, colCorrA, colCorrTh, Fin.sum_univ_two, Fin.sum_univ_one, Fin.isValue, Matrix.cons_val_zero, Matrix.cons_val_one, Matrix.cons_val_fin_one, Matrix.head_cons] <;> ring

theorem adj_gp_s_additive_11_ng_unused_param_zero (f : K → K → K → K) (f_d1 : K → K → K → K) (f_d2 : K → K → K → K) (g : K → K → K) (g_d1 : K → K → K) (t y0 a0 b bu th thu v0 : K) :
    Gen.adj_gp_s_additive_11_ng_out_0_3 g g_d1 t y0 a0 b bu th thu v0 = 0 := by
  simp [Gen.adj_gp_s_additive_11_ng_out_0_3]

theorem adj_gp_s_additive_11_ng_graph (f : K → K → K → K) (f_d1 : K → K → K → K) (f_d2 : K → K → K → K) (g : K → K → K) (g_d1 : K → K → K) (t y0 a0 b bu th thu v0 : K) :
    Gen.adj_gp_s_additive_11_ng_rg_out g g_d1 t y0 a0 b bu th thu v0 = 0 ∧
    Gen.adj_gp_s_additive_11_ng_leaf_out g g_d1 t y0 a0 b bu th thu v0 = 1 ∧
    Gen.adj_gp_s_additive_11_ng_rg_z_after g g_d1 t y0 a0 b bu th thu v0 = 0 ∧
    Gen.adj_gp_s_additive_11_ng_leaf_z_after g g_d1 t y0 a0 b bu th thu v0 = 1 := by
  refine ⟨?_, ?_, ?_, ?_⟩ <;> simp only [Gen.adj_gp_s_additive_11_ng_rg_out, Gen.adj_gp_s_additive_11_ng_leaf_out, Gen.adj_gp_s_additive_11_ng_rg_z_after, Gen.adj_gp_s_additive_11_ng_leaf_z_after]

theorem adj_gp_s_additive_11_en_spec (f : K → K → K → K) (f_d1 : K → K → K → K) (f_d2 : K → K → K → K) (g : K → K → K) (g_d1 : K → K → K) (g_d11 : K → K → K) (t y0 a0 b bu th thu v0 : K) :
    Gen.adj_gp_s_additive_11_en_out_0_0 g g_d1 g_d11 t y0 a0 b bu th thu v0
      = gProdY (jet_additive_11 f f_d1 f_d2 g g_d1 t y0 th) ![v0] 0 ∧
    Gen.adj_gp_s_additive_11_en_out_0_1 g g_d1 g_d11 t y0 a0 b bu th thu v0
      = gProdA (jet_additive_11 f f_d1 f_d2 g g_d1 t y0 th) ![a0] ![v0] 0 ∧
    Gen.adj_gp_s_additive_11_en_out_0_2 g g_d1 g_d11 t y0 a0 b bu th thu v0
      = gProdTh (jet_additive_11 f f_d1 f_d2 g g_d1 t y0 th) ![a0] ![v0] 0 ∧
    Gen.adj_gp_s_additive_11_en_out_0_3 g g_d1 g_d11 t y0 a0 b bu th thu v0
      = gProdTh (jet_additive_11 f f_d1 f_d2 g g_d1 t y0 th) ![a0] ![v0] 1 := by
  refine ⟨?_, ?_, ?_, ?_⟩ <;>
  simp [Gen.adj_gp_s_additive_11_en_out_0_0, Gen.adj_gp_s_additive_11_en_out_0_1, Gen.adj_gp_s_additive_11_en_out_0_2, Gen.adj_gp_s_additive_11_en_out_0_3, jet_additive_11, stratDriftY, stratDriftA, stratDriftTh, itoDriftY, itoDriftA, itoDriftTh, gProdY, gProdA, gProdTh, gdgY, gdgA, gdgTh, driftY, driftA, driftTh, diffY, diffA, diffTh, itoCorr, itoCorrY, itoCorrTh, fStrat, fStratY, fStratTh, colCorrY, colCorrA, colCorrTh, Fin.sum_univ_two, Fin.sum_univ_one, Fin.isValue, Matrix.cons_val_zero, Matrix.cons_val_one, Matrix.cons_val_fin_one, Matrix.head_cons] <;> ring

theorem adj_gp_s_additive_11_en_unused_param_zero (f : K → K → K → K) (f_d1 : K → K → K → K) (f_d2 : K → K → K → K) (g : K → K → K) (g_d1 : K → K → K) (g_d11 : K → K → K) (t y0 a0 b bu th thu v0 : K) :
    Gen.adj_gp_s_additive_11_en_out_0_3 g g_d1 g_d11 t y0 a0 b bu th thu v0 = 0 := by
  simp [Gen.adj_gp_s_additive_11_en_out_0_3]

theorem adj_gp_s_additive_11_en_graph (f : K → K → K → K) (f_d1 : K → K → K → K) (f_d2 : K → K → K → K) (g : K → K → K) (g_d1 : K → K → K) (g_d11 : K → K → K) (t y0 a0 b bu th thu v0 : K) :
    Gen.adj_gp_s_additive_11_en_rg_out g g_d1 g_d11 t y0 a0 b bu th thu v0 = 1 ∧
    Gen.adj_gp_s_additive_11_en_leaf_out g g_d1 g_d11 t y0 a0 b bu th thu v0 = 0 ∧
    Gen.adj_gp_s_additive_11_en_rg_z_after g g_d1 g_d11 t y0 a0 b bu th thu v0 = 1 ∧
    Gen.adj_gp_s_additive_11_en_leaf_z_after g g_d1 g_d11 t y0 a0 b bu th thu v0 = 1 := by
  refine ⟨?_, ?_, ?_, ?_⟩ <;> simp only [Gen.adj_gp_s_additive_11_en_rg_out, Gen.adj_gp_s_additive_11_en_leaf_out, Gen.adj_gp_s_additive_11_en_rg_z_after, Gen.adj_gp_s_additive_11_en_leaf_z_after]

theorem adj_fgp_s_additive_11_ng_unused_param_zero (f : K → K → K → K) (f_d1 : K → K → K → K) (f_d2 : K → K → K → K) (g : K → K → K) (g_d1 : K → K → K) (t y0 a0 b bu th thu v0 : K) :
    Gen.adj_fgp_s_additive_11_ng_f_0_3 f f_d1 f_d2 g g_d1 t y0 a0 b bu th thu v0 = 0 ∧
    Gen.adj_fgp_s_additive_11_ng_gp_0_3 f f_d1 f_d2 g g_d1 t y0 a0 b bu th thu v0 = 0 := by
  refine ⟨?_, ?_⟩ <;> simp [Gen.adj_fgp_s_additive_11_ng_f_0_3, Gen.adj_fgp_s_additive_11_ng_gp_0_3]

theorem adj_fgp_s_additive_11_ng_pair (f : K → K → K → K) (f_d1 : K → K → K → K) (f_d2 : K → K → K → K) (g : K → K → K) (g_d1 : K → K → K) (t y0 a0 b bu th thu v0 : K) :
    Gen.adj_fgp_s_additive_11_ng_f_0_0 f f_d1 f_d2 g g_d1 t y0 a0 b bu th thu v0
      = Gen.adj_f_s_additive_11_ng_out_0_0 f f_d1 f_d2 t y0 a0 b bu th thu ∧
    Gen.adj_fgp_s_additive_11_ng_f_0_1 f f_d1 f_d2 g g_d1 t y0 a0 b bu th thu v0
      = Gen.adj_f_s_additive_11_ng_out_0_1 f f_d1 f_d2 t y0 a0 b bu th thu ∧
    Gen.adj_fgp_s_additive_11_ng_f_0_2 f f_d1 f_d2 g g_d1 t y0 a0 b bu th thu v0
      = Gen.adj_f_s_additive_11_ng_out_0_2 f f_d1 f_d2 t y0 a0 b bu th thu ∧
    Gen.adj_fgp_s_additive_11_ng_f_0_3 f f_d1 f_d2 g g_d1 t y0 a0 b bu th thu v0
      = Gen.adj_f_s_additive_11_ng_out_0_3 f f_d1 f_d2 t y0 a0 b bu th thu ∧
    Gen.adj_fgp_s_additive_11_ng_gp_0_0 f f_d1 f_d2 g g_d1 t y0 a0 b bu th thu v0
      = Gen.adj_gp_s_additive_11_ng_out_0_0 g g_d1 t y0 a0 b bu th thu v0 ∧
    Gen.adj_fgp_s_additive_11_ng_gp_0_1 f f_d1 f_d2 g g_d1 t y0 a0 b bu th thu v0
      = Gen.adj_gp_s_additive_11_ng_out_0_1 g g_d1 t y0 a0 b bu th thu v0 ∧
    Gen.adj_fgp_s_additive_11_ng_gp_0_2 f f_d1 f_d2 g g_d1 t y0 a0 b bu th thu v0
      = Gen.adj_gp_s_additive_11_ng_out_0_2 g g_d1 t y0 a0 b bu th thu v0 ∧
    Gen.adj_fgp_s_additive_11_ng_gp_0_3 f f_d1 f_d2 g g_d1 t y0 a0 b bu th thu v0
      = Gen.adj_gp_s_additive_11_ng_out_0_3 g g_d1 t y0 a0 b bu th thu v0 := by
  refine ⟨?_, ?_, ?_, ?_, ?_, ?_, ?_, ?_⟩ <;> simp only [Gen.adj_fgp_s_additive_11_ng_f_0_0, Gen.adj_f_s_additive_11_ng_out_0_0, Gen.adj_fgp_s_additive_11_ng_f_0_1, Gen.adj_f_s_additive_11_ng_out_0_1, Gen.adj_fgp_s_additive_11_ng_f_0_2, Gen.adj_f_s_additive_11_ng_out_0_2, Gen.adj_fgp_s_additive_11_ng_f_0_3, Gen.adj_f_s_additive_11_ng_out_0_3, Gen.adj_fgp_s_additive_11_ng_gp_0_0, Gen.adj_gp_s_additive_11_ng_out_0_0, Gen.adj_fgp_s_additive_11_ng_gp_0_1, Gen.adj_gp_s_additive_11_ng_out_0_1, Gen.adj_fgp_s_additive_11_ng_gp_0_2, Gen.adj_gp_s_additive_11_ng_out_0_2, Gen.adj_fgp_s_additive_11_ng_gp_0_3, Gen.adj_gp_s_additive_11_ng_out_0_3] <;> ring

theorem adj_fgp_s_additive_11_ng_graph (f : K → K → K → K) (f_d1 : K → K → K → K) (f_d2 : K → K → K → K) (g : K → K → K) (g_d1 : K → K → K) (t y0 a0 b bu th thu v0 : K) :
    Gen.adj_fgp_s_additive_11_ng_rg_f f f_d1 f_d2 g g_d1 t y0 a0 b bu th thu v0 = 0 ∧
    Gen.adj_fgp_s_additive_11_ng_leaf_f f f_d1 f_d2 g g_d1 t y0 a0 b bu th thu v0 = 1 ∧
    Gen.adj_fgp_s_additive_11_ng_rg_gp f f_d1 f_d2 g g_d1 t y0 a0 b bu th thu v0 = 0 ∧
    Gen.adj_fgp_s_additive_11_ng_leaf_gp f f_d1 f_d2 g g_d1 t y0 a0 b bu th thu v0 = 1 ∧
    Gen.adj_fgp_s_additive_11_ng_rg_z_after f f_d1 f_d2 g g_d1 t y0 a0 b bu th thu v0 = 0 ∧
    Gen.adj_fgp_s_additive_11_ng_leaf_z_after f f_d1 f_d2 g g_d1 t y0 a0 b bu th thu v0 = 1 := by
  refine ⟨?_, ?_, ?_, ?_, ?_, ?_⟩ <;> simp only [Gen.adj_fgp_s_additive_11_ng_rg_f, Gen.adj_fgp_s_additive_11_ng_leaf_f, Gen.adj_fgp_s_additive_11_ng_rg_gp, Gen.adj_fgp_s_additive_11_ng_leaf_gp, Gen.adj_fgp_s_additive_11_ng_rg_z_after, Gen.adj_fgp_s_additive_11_ng_leaf_z_after]

theorem adj_fgp_s_additive_11_en_unused_param_zero (f : K → K → K → K) (f_d1 : K → K → K → K) (f_d2 : K → K → K → K) (g : K → K → K) (g_d1 : K → K → K) (t y0 a0 b bu th thu v0 : K) :
    Gen.adj_fgp_s_additive_11_en_f_0_3 f f_d1 f_d2 g g_d1 t y0 a0 b bu th thu v0 = 0 ∧
    Gen.adj_fgp_s_additive_11_en_gp_0_3 f f_d1 f_d2 g g_d1 t y0 a0 b bu th thu v0 = 0 := by
  refine ⟨?_, ?_⟩ <;> simp [Gen.adj_fgp_s_additive_11_en_f_0_3, Gen.adj_fgp_s_additive_11_en_gp_0_3]

theorem adj_fgp_s_additive_11_en_pair (f : K → K → K → K) (f_d1 : K → K → K → K) (f_d2 : K → K → K → K) (g : K → K → K) (g_d1 : K → K → K) (t y0 a0 b bu th thu v0 : K) :
    Gen.adj_fgp_s_additive_11_en_f_0_0 f f_d1 f_d2 g g_d1 t y0 a0 b bu th thu v0
      = Gen.adj_f_s_additive_11_en_out_0_0 f f_d1 f_d11 f_d12 f_d2 f_d22 t y0 a0 b bu th thu ∧
    Gen.adj_fgp_s_additive_11_en_f_0_1 f f_d1 f_d2 g g_d1 t y0 a0 b bu th thu v0
      = Gen.adj_f_s_additive_11_en_out_0_1 f f_d1 f_d11 f_d12 f_d2 f_d22 t y0 a0 b bu th thu ∧
    Gen.adj_fgp_s_additive_11_en_f_0_2 f f_d1 f_d2 g g_d1 t y0 a0 b bu th thu v0
      = Gen.adj_f_s_additive_11_en_out_0_2 f f_d1 f_d11 f_d12 f_d2 f_d22 t y0 a0 b bu th thu ∧
    Gen.adj_fgp_s_additive_11_en_f_0_3 f f_d1 f_d2 g g_d1 t y0 a0 b bu th thu v0
      = Gen.adj_f_s_additive_11_en_out_0_3 f f_d1 f_d11 f_d12 f_d2 f_d22 t y0 a0 b bu th thu ∧
    Gen.adj_fgp_s_additive_11_en_gp_0_0 f f_d1 f_d2 g g_d1 t y0 a0 b bu th thu v0
      = Gen.adj_gp_s_additive_11_en_out_0_0 g g_d1 g_d11 t y0 a0 b bu th thu v0 ∧
    Gen.adj_fgp_s_additive_11_en_gp_0_1 f f_d1 f_d2 g g_d1 t y0 a0 b bu th thu v0
      = Gen.adj_gp_s_additive_11_en_out_0_1 g g_d1 g_d11 t y0 a0 b bu th thu v0 ∧
    Gen.adj_fgp_s_additive_11_en_gp_0_2 f f_d1 f_d2 g g_d1 t y0 a0 b bu th thu v0
      = Gen.adj_gp_s_additive_11_en_out_0_2 g g_d1 g_d11 t y0 a0 b bu th thu v0 ∧
    Gen.adj_fgp_s_additive_11_en_gp_0_3 f f_d1 f_d2 g g_d1 t y0 a0 b bu th thu v0
      = Gen.adj_gp_s_additive_11_en_out_0_3 g g_d1 g_d11 t y0 a0 b bu th thu v0 := by
  refine ⟨?_, ?_, ?_, ?_, ?_, ?_, ?_, ?_⟩ <;> simp only [Gen.adj_fgp_s_additive_11_en_f_0_0, Gen.adj_f_s_additive_11_en_out_0_0, Gen.adj_fgp_s_additive_11_en_f_0_1, Gen.adj_f_s_additive_11_en_out_0_1, Gen.adj_fgp_s_additive_11_en_f_0_2, Gen.adj_f_s_additive_11_en_out_0_2, Gen.adj_fgp_s_additive_11_en_f_0_3, Gen.adj_f_s_additive_11_en_out_0_3, Gen.adj_fgp_s_additive_11_en_gp_0_0, Gen.adj_gp_s_additive_11_en_out_0_0, Gen.adj_fgp_s_additive_11_en_gp_0_1, Gen.adj_gp_s_additive_11_en_out_0_1, Gen.adj_fgp_s_additive_11_en_gp_0_2, Gen.adj_gp_s_additive_11_en_out_0_2, Gen.adj_fgp_s_additive_11_en_gp_0_3, Gen.adj_gp_s_additive_11_en_out_0_3] <;> ring

theorem adj_fgp_s_additive_11_en_graph (f : K → K → K → K) (f_d1 : K → K → K → K) (f_d2 : K → K → K → K) (g : K → K → K) (g_d1 : K → K → K) (t y0 a0 b bu th thu v0 : K) :
    Gen.adj_fgp_s_additive_11_en_rg_f f f_d1 f_d2 g g_d1 t y0 a0 b bu th thu v0 = 1 ∧
    Gen.adj_fgp_s_additive_11_en_leaf_f f f_d1 f_d2 g g_d1 t y0 a0 b bu th thu v0 = 0 ∧
    Gen.adj_fgp_s_additive_11_en_rg_gp f f_d1 f_d2 g g_d1 t y0 a0 b bu th thu v0 = 1 ∧
    Gen.adj_fgp_s_additive_11_en_leaf_gp f f_d1 f_d2 g g_d1 t y0 a0 b bu th thu v0 = 0 ∧
    Gen.adj_fgp_s_additive_11_en_rg_z_after f f_d1 f_d2 g g_d1 t y0 a0 b bu th thu v0 = 1 ∧
    Gen.adj_fgp_s_additive_11_en_leaf_z_after f f_d1 f_d2 g g_d1 t y0 a0 b bu th thu v0 = 1 := by
  refine ⟨?_, ?_, ?_, ?_, ?_, ?_⟩ <;> simp only [Gen.adj_fgp_s_additive_11_en_rg_f, Gen.adj_fgp_s_additive_11_en_leaf_f, Gen.adj_fgp_s_additive_11_en_rg_gp, Gen.adj_fgp_s_additive_11_en_leaf_gp, Gen.adj_fgp_s_additive_11_en_rg_z_after, Gen.adj_fgp_s_additive_11_en_leaf_z_after]

theorem adj_f_s_scalar_11_ng_spec (f : K → K → K → K) (f_d1 : K → K → K → K) (f_d2 : K → K → K → K) (g : K → K → K → K) (g_d1 : K → K → K → K) (g_d11 : K → K → K → K) (g_d12 : K → K → K → K) (g_d2 : K → K → K → K) (t y0 a0 b bu th thu : K) :
    Gen.adj_f_s_scalar_11_ng_out_0_0 f f_d1 f_d2 t y0 a0 b bu th thu
      = stratDriftY (jet_scalar_11 f f_d1 f_d2 g g_d1 g_d11 g_d12 g_d2 t y0 th) 0 ∧
    Gen.adj_f_s_scalar_11_ng_out_0_1 f f_d1 f_d2 t y0 a0 b bu th thu
      = stratDriftA (jet_scalar_11 f f_d1 f_d2 g g_d1 g_d11 g_d12 g_d2 t y0 th) ![a0] 0 ∧
    Gen.adj_f_s_scalar_11_ng_out_0_2 f f_d1 f_d2 t y0 a0 b bu th thu
      = stratDriftTh (jet_scalar_11 f f_d1 f_d2 g g_d1 g_d11 g_d12 g_d2 t y0 th) ![a0] 0 ∧
    Gen.adj_f_s_scalar_11_ng_out_0_3 f f_d1 f_d2 t y0 a0 b bu th thu
      = stratDriftTh (jet_scalar_11 f f_d1 f_d2 g g_d1 g_d11 g_d12 g_d2 t y0 th) ![a0] 1 := by
  refine ⟨?_, ?_, ?_, ?_⟩ <;>
  simp [Gen.adj_f_s_scalar_11_ng_out_0_0, Gen.adj_f_s_scalar_11_ng_out_0_1, Gen.adj_f_s_scalar_11_ng_out_0_2, Gen.adj_f_s_scalar_11_ng_out_0_3, jet_scalar_11, stratDriftY, stratDriftA, stratDriftTh, itoDriftY, itoDriftA, itoDriftTh, gProdY, gProdA, gProdTh, gdgY, gdgA, gdgTh, driftY, driftA, driftTh, diffY, diffA, diffTh, itoCorr, itoCorrY, itoCorrTh, fStrat, fStratY, fStratTh, colCorrY, colCorrA, colCorrTh, Fin.sum_univ_two, Fin.sum_univ_one, Fin.isValue, Matrix.cons_val_zero, Matrix.cons_val_one, Matrix.cons_val_fin_one, Matrix.head_cons] <;> ring

theorem adj_f_s_scalar_11_ng_unused_param_zero (f : K → K → K → K) (f_d1 : K → K → K → K) (f_d2 : K → K → K → K) (g : K → K → K → K) (g_d1 : K → K → K → K) (g_d11 : K → K → K → K) (g_d12 : K → K → K → K) (g_d2 : K → K → K → K) (t y0 a0 b bu th thu : K) :
    Gen.adj_f_s_scalar_11_ng_out_0_3 f f_d1 f_d2 t y0 a0 b bu th thu = 0 := by
  simp [Gen.adj_f_s_scalar_11_ng_out_0_3]

theorem adj_f_s_scalar_11_ng_graph (f : K → K → K → K) (f_d1 : K → K → K → K) (f_d2 : K → K → K → K) (g : K → K → K → K) (g_d1 : K → K → K → K) (g_d11 : K → K → K → K) (g_d12 : K → K → K → K) (g_d2 : K → K → K → K) (t y0 a0 b bu th thu : K) :
    Gen.adj_f_s_scalar_11_ng_rg_out f f_d1 f_d2 t y0 a0 b bu th thu = 0 ∧
    Gen.adj_f_s_scalar_11_ng_leaf_out f f_d1 f_d2 t y0 a0 b bu th thu = 1 ∧
    Gen.adj_f_s_scalar_11_ng_rg_z_after f f_d1 f_d2 t y0 a0 b bu th thu = 0 ∧
    Gen.adj_f_s_scalar_11_ng_leaf_z_after f f_d1 f_d2 t y0 a0 b bu th thu = 1 := by
  refine ⟨?_, ?_, ?_, ?_⟩ <;> simp only [Gen.adj_f_s_scalar_11_ng_rg_out, Gen.adj_f_s_scalar_11_ng_leaf_out, Gen.adj_f_s_scalar_11_ng_rg_z_after, Gen.adj_f_s_scalar_11_ng_leaf_z_after]

theorem adj_f_s_scalar_11_en_spec (f : K → K → K → K) (f_d1 : K → K → K → K) (f_d11 : K → K → K → K) (f_d12 : K → K → K → K) (f_d2 : K → K → K → K) (f_d22 : K → K → K → K) (g : K → K → K → K) (g_d1 : K → K → K → K) (g_d11 : K → K → K → K) (g_d12 : K → K → K → K) (g_d2 : K → K → K → K) (t y0 a0 b bu th thu : K) :
    Gen.adj_f_s_scalar_11_en_out_0_0 f f_d1 f_d11 f_d12 f_d2 f_d22 t y0 a0 b bu th thu
      = stratDriftY (jet_scalar_11 f f_d1 f_d2 g g_d1 g_d11 g_d12 g_d2 t y0 th) 0 ∧
    Gen.adj_f_s_scalar_11_en_out_0_1 f f_d1 f_d11 f_d12 f_d2 f_d22 t y0 a0 b bu th thu
      = stratDriftA (jet_scalar_11 f f_d1 f_d2 g g_d1 g_d11 g_d12 g_d2 t y0 th) ![a0] 0 ∧
    Gen.adj_f_s_scalar_11_en_out_0_2 f f_d1 f_d11 f_d12 f_d2 f_d22 t y0 a0 b bu th thu
      = stratDriftTh (jet_scalar_11 f f_d1 f_d2 g g_d1 g_d11 g_d12 g_d2 t y0 th) ![a0] 0 ∧
    Gen.adj_f_s_scalar_11_en_out_0_3 f f_d1 f_d11 f_d12 f_d2 f_d22 t y0 a0 b bu th thu
      = stratDriftTh (jet_scalar_11 f f_d1 f_d2 g g_d1 g_d11 g_d12 g_d2 t y0 th) ![a0] 1 := by
  refine ⟨?_, ?_, ?_, ?_⟩ <;>
  simp [Gen.adj_f_s_scalar_11_en_out_0_0, Gen.adj_f_s_scalar_11_en_out_0_1, Gen.adj_f_s_scalar_11_en_out_0_2, Gen.adj_f_s_scalar_11_en_out_0_3, jet_scalar_11, stratDriftY, stratDriftA, stratDriftTh, itoDriftY, itoDriftA, itoDriftTh, gProdY, gProdA, gProdTh, gdgY, gdgA, gdgTh, driftY, driftA, driftTh, diffY, diffA, diffTh, itoCorr, itoCorrY, itoCorrTh, fStrat, fStratY, fStratTh, colCorrY, colCorrA, colCorrTh, Fin.sum_univ_two, Fin.sum_univ_one, Fin.isValue, Matrix.cons_val_zero, Matrix.cons_val_one, Matrix.cons_val_fin_one, Matrix.head_cons] <;> ring

theorem adj_f_s_scalar_11_en_unused_param_zero (f : K → K → K → K) (f_d1 : K → K → K → K) (f_d11 : K → K → K → K) (f_d12 : K → K → K → K) (f_d2 : K → K → K → K) (f_d22 : K → K → K → K) (g : K → K → K → K) (g_d1 : K → K → K → K) (g_d11 : K → K → K → K) (g_d12 : K → K → K → K) (g_d2 : K → K → K → K) (t y0 a0 b bu th thu : K) :
    Gen.adj_f_s_scalar_11_en_out_0_3 f f_d1 f_d11 f_d12 f_d2 f_d22 t y0 a0 b bu th thu = 0 := by
  simp [Gen.adj_f_s_scalar_11_en_out_0_3]

theorem adj_f_s_scalar_11_en_graph (f : K → K → K → K) (f_d1 : K → K → K → K) (f_d11 : K → K → K → K) (f_d12 : K → K → K → K) (f_d2 : K → K → K → K) (f_d22 : K → K → K → K) (g : K → K → K → K) (g_d1 : K → K → K → K) (g_d11 : K → K → K → K) (g_d12 : K → K → K → K) (g_d2 : K → K → K → K) (t y0 a0 b bu th thu : K) :
    Gen.adj_f_s_scalar_11_en_rg_out f f_d1 f_d11 f_d12 f_d2 f_d22 t y0 a0 b bu th thu = 1 ∧
    Gen.adj_f_s_scalar_11_en_leaf_out f f_d1 f_d11 f_d12 f_d2 f_d22 t y0 a0 b bu th thu = 0 ∧
    Gen.adj_f_s_scalar_11_en_rg_z_after f f_d1 f_d11 f_d12 f_d2 f_d22 t y0 a0 b bu th thu = 1 ∧
    Gen.adj_f_s_scalar_11_en_leaf_z_after f f_d1 f_d11 f_d12 f_d2 f_d22 t y0 a0 b bu th thu = 1 := by
  refine ⟨?_, ?_, ?_, ?_⟩ <;> simp only [Gen.adj_f_s_scalar_11_en_rg_out, Gen.adj_f_s_scalar_11_en_leaf_out, Gen.adj_f_s_scalar_11_en_rg_z_after, Gen.adj_f_s_scalar_11_en_leaf_z_after]

theorem adj_gp_s_scalar_11_ng_spec (f : K → K → K → K) (f_d1 : K → K → K → K) (f_d2 : K → K → K → K) (g : K → K → K → K) (g_d1 : K → K → K → K) (g_d11 : K → K → K → K) (g_d12 : K → K → K → K) (g_d2 : K → K → K → K) (t y0 a0 b bu th thu v0 : K) :
    Gen.adj_gp_s_scalar_11_ng_out_0_0 g g_d1 g_d2 t y0 a0 b bu th thu v0
      = gProdY (jet_scalar_11 f f_d1 f_d2 g g_d1 g_d11 g_d12 g_d2 t y0 th) ![v0] 0 ∧
    Gen.adj_gp_s_scalar_11_ng_out_0_1 g g_d1 g_d2 t y0 a0 b bu th thu v0
      = gProdA (jet_scalar_11 f f_d1 f_d2 g g_d1 g_d11 g_d12 g_d2 t y0 th) ![a0] ![v0] 0 ∧
    Gen.adj_gp_s_scalar_11_ng_out_0_2 g g_d1 g_d2 t y0 a0 b bu th thu v0
      = gProdTh (jet_scalar_11 f f_d1 f_d2 g g_d1 g_d11 g_d12 g_d2 t y0 th) ![a0] ![v0] 0 ∧
    Gen.adj_gp_s_scalar_11_ng_out_0_3 g g_d1 g_d2 t y0 a0 b bu th thu v0
      = gProdTh (jet_scalar_11 f f_d1 f_d2 g g_d1 g_d11 g_d12 g_d2 t y0 th) ![a0] ![v0] 1 := by
  refine ⟨?_, ?_, ?_, ?_⟩ <;>
  simp [Gen.adj_gp_s_scalar_11_ng_out_0_0, Gen.adj_gp_s_scalar_11_ng_out_0_1, Gen.adj_gp_s_scalar_11_ng_out_0_2, Gen.adj_gp_s_scalar_11_ng_out_0_3, jet_scalar_11, stratDriftY, stratDriftA, stratDriftTh, itoDriftY, itoDriftA, itoDriftTh, gProdY, gProdA, gProdTh, gdgY, gdgA, gdgTh, driftY, driftA, driftTh, diffY, diffA, diffTh, itoCorr, itoCorrY, itoCorrTh, fStrat, fStratY, fStratTh, colCorrY, colCorrA, colCorrTh, Fin.sum_univ_two, Fin.sum_univ_one, Fin.isValue, Matrix.cons_val_zero, Matrix.cons_val_one, Matrix.cons_val_fin_one, Matrix.head_cons] <;> ring

theorem adj_gp_s_scalar_11_ng_unused_param_zero (f : K → K → K → K) (f_d1 : K → K → K → K) (f_d2 : K → K → K → K) (g : K → K → K → K) (g_d1 : K → K → K → K) (g_d11 : K → K → K → K) (g_d12 : K → K → K → K) (g_d2 : K → K → K → K) (t y0 a0 b bu th thu v0 : K) :
    Gen.adj_gp_s_scalar_11_ng_out_0_3 g g_d1 g_d2 t y0 a0 b bu th thu v0 = 0 := by
  simp [Gen.adj_gp_s_scalar_11_ng_out_0_3]

theorem adj_gp_s_scalar_11_ng_graph (f : K → K → K → K) (f_d1 : K → K → K → K) (f_d2 : K → K → K → K) (g : K → K → K → K) (g_d1 : K → K → K → K) (g_d11 : K → K → K → K) (g_d12 : K → K → K → K) (g_d2 : K → K → K → K) (t y0 a0 b bu th thu v0 : K) :
    Gen.adj_gp_s_scalar_11_ng_rg_out g g_d1 g_d2 t y0 a0 b bu th thu v0 = 0 ∧
    Gen.adj_gp_s_scalar_11_ng_leaf_out g g_d1 g_d2 t y0 a0 b bu th thu v0 = 1 ∧
    Gen.adj_gp_s_scalar_11_ng_rg_z_after g g_d1 g_d2 t y0 a0 b bu th thu v0 = 0 ∧
    Gen.adj_gp_s_scalar_11_ng_leaf_z_after g g_d1 g_d2 t y0 a0 b bu th thu v0 = 1 := by
  refine ⟨?_, ?_, ?_, ?_⟩ <;> simp only [Gen.adj_gp_s_scalar_11_ng_rg_out, Gen.adj_gp_s_scalar_11_ng_leaf_out, Gen.adj_gp_s_scalar_11_ng_rg_z_after, Gen.adj_gp_s_scalar_11_ng_leaf_z_after]

theorem adj_gp_s_scalar_11_en_spec (f : K → K → K → K) (f_d1 : K → K → K → K) (f_d2 : K → K → K → K) (g : K → K → K → K) (g_d1 : K → K → K → K) (g_d11 : K → K → K → K) (g_d12 : K → K → K → K) (g_d2 : K → K → K → K) (g_d22 : K → K → K → K) (t y0 a0 b bu th thu v0 : K) :
    Gen.adj_gp_s_scalar_11_en_out_0_0 g g_d1 g_d11 g_d12 g_d2 g_d22 t y0 a0 b bu th thu v0
      = gProdY (jet_scalar_11 f f_d1 f_d2 g g_d1 g_d11 g_d12 g_d2 t y0 th) ![v0] 0 ∧
    Gen.adj_gp_s_scalar_11_en_out_0_1 g g_d1 g_d11 g_d12 g_d2 g_d22 t y0 a0 b bu th thu v0
      = gProdA (jet_scalar_11 f f_d1 f_d2 g g_d1 g_d11 g_d12 g_d2 t y0 th) ![a0] ![v0] 0 ∧
    Gen.adj_gp_s_scalar_11_en_out_0_2 g g_d1 g_d11 g_d12 g_d2 g_d22 t y0 a0 b bu th thu v0
      = gProdTh (jet_scalar_11 f f_d1 f_d2 g g_d1 g_d11 g_d12 g_d2 t y0 th) ![a0] ![v0] 0 ∧
    Gen.adj_gp_s_scalar_11_en_out_0_3 g g_d1 g_d11 g_d12 g_d2 g_d22 t y0 a0 b bu th thu v0
      = gProdTh (jet_scalar_11 f f_d1 f_d2 g g_d1 g_d11 g_d12 g_d2 t y0 th) ![a0] ![v0] 1 := by
  refine ⟨?_, ?_, ?_, ?_⟩ <;>
  simp [Gen.adj_gp_s_scalar_11_en_out_0_0, Gen.adj_gp_s_scalar_11_en_out_0_1, Gen.adj_gp_s_scalar_11_en_out_0_2, Gen.adj_gp_s_scalar_11_en_out_0_3, jet_scalar_11, stratDriftY, stratDriftA, stratDriftTh, itoDriftY, itoDriftA, itoDriftTh, gProdY, gProdA, gProdTh, gdgY, gdgA, gdgTh, driftY, driftA, driftTh, diffY, diffA, diffTh, itoCorr, itoCorrY, itoCorrTh, fStrat, fStratY, fStratTh, colCorrY, colCorrA, colCorrTh, Fin.sum_univ_two, Fin.sum_univ_one, Fin.isValue, Matrix.cons_val_zero, Matrix.cons_val_one, Matrix.cons_val_fin_one, Matrix.head_cons] <;> ring

theorem adj_gp_s_scalar_11_en_unused_param_zero (f : K → K → K → K) (f_d1 : K → K → K → K) (f_d2 : K → K → K → K) (g : K → K → K → K) (g_d1 : K → K → K → K) (g_d11 : K → K → K → K) (g_d12 : K → K → K → K) (g_d2 : K → K → K → K) (g_d22 : K → K → K → K) (t y0 a0 b bu th thu v0 : K) :
    Gen.adj_gp_s_scalar_11_en_out_0_3 g g_d1 g_d11 g_d12 g_d2 g_d22 t y0 a0 b bu th thu v0 = 0 := by
  simp [Gen.adj_gp_s_scalar_11_en_out_0_3]

theorem adj_gp_s_scalar_11_en_graph (f : K → K → K → K) (f_d1 : K → K → K → K) (f_d2 : K → K → K → K) (g : K → K → K → K) (g_d1 : K → K → K → K) (g_d11 : K → K → K → K) (g_d12 : K → K → K → K) (g_d2 : K → K → K → K) (g_d22 : K → K → K → K) (t y0 a0 b bu th thu v0 : K) :
    Gen.adj_gp_s_scalar_11_en_rg_out g g_d1 g_d11 g_d12 g_d2 g_d22 t y0 a0 b bu th thu v0 = 1 ∧
    Gen.adj_gp_s_scalar_11_en_leaf_out g g_d1 g_d11 g_d12 g_d2 g_d22 t y0 a0 b bu th thu v0 = 0 ∧
    Gen.adj_gp_s_scalar_11_en_rg_z_after g g_d1 g_d11 g_d12 g_d2 g_d22 t y0 a0 b bu th thu v0 = 1 ∧
    Gen.adj_gp_s_scalar_11_en_leaf_z_after g g_d1 g_d11 g_d12 g_d2 g_d22 t y0 a0 b bu th thu v0 = 1 := by
  refine ⟨?_, ?_, ?_, ?_⟩ <;> simp only [Gen.adj_gp_s_scalar_11_en_rg_out, Gen.adj_gp_s_scalar_11_en_leaf_out, Gen.adj_gp_s_scalar_11_en_rg_z_after, Gen.adj_gp_s_scalar_11_en_leaf_z_after]

theorem adj_fgp_s_scalar_11_ng_unused_param_zero (f : K → K → K → K) (f_d1 : K → K → K → K) (f_d2 : K → K → K → K) (g : K → K → K → K) (g_d1 : K → K → K → K) (g_d11 : K → K → K → K) (g_d12 : K → K → K → K) (g_d2 : K → K → K → K) (t y0 a0 b bu th thu v0 : K) :
    Gen.adj_fgp_s_scalar_11_ng_f_0_3 f f_d1 f_d2 g g_d1 g_d2 t y0 a0 b bu th thu v0 = 0 ∧
    Gen.adj_fgp_s_scalar_11_ng_gp_0_3 f f_d1 f_d2 g g_d1 g_d2 t y0 a0 b bu th thu v0 = 0 := by
  refine ⟨?_, ?_⟩ <;> simp [Gen.adj_fgp_s_scalar_11_ng_f_0_3, Gen.adj_fgp_s_scalar_11_ng_gp_0_3]

theorem adj_fgp_s_scalar_11_ng_pair (f : K → K → K → K) (f_d1 : K → K → K → K) (f_d2 : K → K → K → K) (g : K → K → K → K) (g_d1 : K → K → K → K) (g_d11 : K → K → K → K) (g_d12 : K → K → K → K) (g_d2 : K → K → K → K) (t y0 a0 b bu th thu v0 : K) :
    Gen.adj_fgp_s_scalar_11_ng_f_0_0 f f_d1 f_d2 g g_d1 g_d2 t y0 a0 b bu th thu v0
      = Gen.adj_f_s_scalar_11_ng_out_0_0 f f_d1 f_d2 t y0 a0 b bu th thu ∧
    Gen.adj_fgp_s_scalar_11_ng_f_0_1 f f_d1 f_d2 g g_d1 g_d2 t y0 a0 b bu th thu v0
      = Gen.adj_f_s_scalar_11_ng_out_0_1 f f_d1 f_d2 t y0 a0 b bu th thu ∧
    Gen.adj_fgp_s_scalar_11_ng_f_0_2 f f_d1 f_d2 g g_d1 g_d2 t y0 a0 b bu th thu v0
      = Gen.adj_f_s_scalar_11_ng_out_0_2 f f_d1 f_d2 t y0 a0 b bu th thu ∧
    Gen.adj_fgp_s_scalar_11_ng_f_0_3 f f_d1 f_d2 g g_d1 g_d2 t y0 a0 b bu th thu v0
      = Gen.adj_f_s_scalar_11_ng_out_0_3 f f_d1 f_d2 t y0 a0 b bu th thu ∧
    Gen.adj_fgp_s_scalar_11_ng_gp_0_0 f f_d1 f_d2 g g_d1 g_d2 t y0 a0 b bu th thu v0
      = Gen.adj_gp_s_scalar_11_ng_out_0_0 g g_d1 g_d2 t y0 a0 b bu th thu v0 ∧
    Gen.adj_fgp_s_scalar_11_ng_gp_0_1 f f_d1 f_d2 g g_d1 g_d2 t y0 a0 b bu th thu v0
      = Gen.adj_gp_s_scalar_11_ng_out_0_1 g g_d1 g_d2 t y0 a0 b bu th thu v0 ∧
    Gen.adj_fgp_s_scalar_11_ng_gp_0_2 f f_d1 f_d2 g g_d1 g_d2 t y0 a0 b bu th thu v0
      = Gen.adj_gp_s_scalar_11_ng_out_0_2 g g_d1 g_d2 t y0 a0 b bu th thu v0 ∧
    Gen.adj_fgp_s_scalar_11_ng_gp_0_3 f f_d1 f_d2 g g_d1 g_d2 t y0 a0 b bu th thu v0
      = Gen.adj_gp_s_scalar_11_ng_out_0_3 g g_d1 g_d2 t y0 a0 b bu th thu v0 := by
  refine ⟨?_, ?_, ?_, ?_, ?_, ?_, ?_, ?_⟩ <;> simp only [Gen.adj_fgp_s_scalar_11_ng_f_0_0, Gen.adj_f_s_scalar_11_ng_out_0_0, Gen.adj_fgp_s_scalar_11_ng_f_0_1, Gen.adj_f_s_scalar_11_ng_out_0_1, Gen.adj_fgp_s_scalar_11_ng_f_0_2, Gen.adj_f_s_scalar_11_ng_out_0_2, Gen.adj_fgp_s_scalar_11_ng_f_0_3, Gen.adj_f_s_scalar_11_ng_out_0_3, Gen.adj_fgp_s_scalar_11_ng_gp_0_0, Gen.adj_gp_s_scalar_11_ng_out_0_0, Gen.adj_fgp_s_scalar_11_ng_gp_0_1, Gen.adj_gp_s_scalar_11_ng_out_0_1, Gen.adj_fgp_s_scalar_11_ng_gp_0_2, Gen.adj_gp_s_scalar_11_ng_out_0_2, Gen.adj_fgp_s_scalar_11_ng_gp_0_3, Gen.adj_gp_s_scalar_11_ng_out_0_3] <;> ring

theorem adj_fgp_s_scalar_11_ng_graph (f : K → K → K → K) (f_d1 : K → K → K → K) (f_d2 : K → K → K → K) (g : K → K → K → K) (g_d1 : K → K → K → K) (g_d11 : K → K → K → K) (g_d12 : K → K → K → K) (g_d2 : K → K → K → K) (t y0 a0 b bu th thu v0 : K) :
    Gen.adj_fgp_s_scalar_11_ng_rg_f f f_d1 f_d2 g g_d1 g_d2 t y0 a0 b bu th thu v0 = 0 ∧
    Gen.adj_fgp_s_scalar_11_ng_leaf_f f f_d1 f_d2 g g_d1 g_d2 t y0 a0 b bu th thu v0 = 1 ∧
    Gen.adj_fgp_s_scalar_11_ng_rg_gp f f_d1 f_d2 g g_d1 g_d2 t y0 a0 b bu th thu v0 = 0 ∧
    Gen.adj_fgp_s_scalar_11_ng_leaf_gp f f_d1 f_d2 g g_d1 g_d2 t y0 a0 b bu th thu v0 = 1 ∧
    Gen.adj_fgp_s_scalar_11_ng_rg_z_after f f_d1 f_d2 g g_d1 g_d2 t y0 a0 b bu th thu v0 = 0 ∧
    Gen.adj_fgp_s_scalar_11_ng_leaf_z_after f f_d1 f_d2 g g_d1 g_d2 t y0 a0 b bu th thu v0 = 1 := by
  refine ⟨?_, ?_, ?_, ?_, ?_, ?_⟩ <;> simp only [Gen.adj_fgp_s_scalar_11_ng_rg_f, Gen.adj_fgp_s_scalar_11_ng_leaf_f, Gen.adj_fgp_s_scalar_11_ng_rg_gp, Gen.adj_fgp_s_scalar_11_ng_leaf_gp, Gen.adj_fgp_s_scalar_11_ng_rg_z_after, Gen.adj_fgp_s_scalar_11_ng_leaf_z_after]

theorem adj_fgp_s_scalar_11_en_unused_param_zero (f : K → K → K → K) (f_d1 : K → K → K → K) (f_d2 : K → K → K → K) (g : K → K → K → K) (g_d1 : K → K → K → K) (g_d11 : K → K → K → K) (g_d12 : K → K → K → K) (g_d2 : K → K → K → K) (t y0 a0 b bu th thu v0 : K) :
    Gen.adj_fgp_s_scalar_11_en_f_0_3 f f_d1 f_d2 g g_d1 g_d2 t y0 a0 b bu th thu v0 = 0 ∧
    Gen.adj_fgp_s_scalar_11_en_gp_0_3 f f_d1 f_d2 g g_d1 g_d2 t y0 a0 b bu th thu v0 = 0 := by
  refine ⟨?_, ?_⟩ <;> simp [Gen.adj_fgp_s_scalar_11_en_f_0_3, Gen.adj_fgp_s_scalar_11_en_gp_0_3]

theorem adj_fgp_s_scalar_11_en_pair (f : K → K → K → K) (f_d1 : K → K → K → K) (f_d2 : K → K → K → K) (g : K → K → K → K) (g_d1 : K → K → K → K) (g_d11 : K → K → K → K) (g_d12 : K → K → K → K) (g_d2 : K → K → K → K) (t y0 a0 b bu th thu v0 : K) :
    Gen.adj_fgp_s_scalar_11_en_f_0_0 f f_d1 f_d2 g g_d1 g_d2 t y0 a0 b bu th thu v0
      = Gen.adj_f_s_scalar_11_en_out_0_0 f f_d1 f_d11 f_d12 f_d2 f_d22 t y0 a0 b bu th thu ∧
    Gen.adj_fgp_s_scalar_11_en_f_0_1 f f_d1 f_d2 g g_d1 g_d2 t y0 a0 b bu th thu v0
      = Gen.adj_f_s_scalar_11_en_out_0_1 f f_d1 f_d11 f_d12 f_d2 f_d22 t y0 a0 b bu th thu ∧
    Gen.adj_fgp_s_scalar_11_en_f_0_2 f f_d1 f_d2 g g_d1 g_d2 t y0 a0 b bu th thu v0
      = Gen.adj_f_s_scalar_11_en_out_0_2 f f_d1 f_d11 f_d12 f_d2 f_d22 t y0 a0 b bu th thu ∧
    Gen.adj_fgp_s_scalar_11_en_f_0_3 f f_d1 f_d2 g g_d1 g_d2 t y0 a0 b bu th thu v0
      = Gen.adj_f_s_scalar_11_en_out_0_3 f f_d1 f_d11 f_d12 f_d2 f_d22 t y0 a0 b bu th thu ∧
    Gen.adj_fgp_s_scalar_11_en_gp_0_0 f f_d1 f_d2 g g_d1 g_d2 t y0 a0 b bu th thu v0
      = Gen.adj_gp_s_scalar_11_en_out_0_0 g g_d1 g_d11 g_d12 g_d2 g_d22 t y0 a0 b bu th thu v0 ∧
    Gen.adj_fgp_s_scalar_11_en_gp_0_1 f f_d1 f_d2 g g_d1 g_d2 t y0 a0 b bu th thu v0
      = Gen.adj_gp_s_scalar_11_en_out_0_1 g g_d1 g_d11 g_d12 g_d2 g_d22 t y0 a0 b bu th thu v0 ∧
    Gen.adj_fgp_s_scalar_11_en_gp_0_2 f f_d1 f_d2 g g_d1 g_d2 t y0 a0 b bu th thu v0
      = Gen.adj_gp_s_scalar_11_en_out_0_2 g g_d1 g_d11 g_d12 g_d2 g_d22 t y0 a0 b bu th thu v0 ∧
    Gen.adj_fgp_s_scalar_11_en_gp_0_3 f f_d1 f_d2 g g_d1 g_d2 t y0 a0 b bu th thu v0
      = Gen.adj_gp_s_scalar_11_en_out_0_3 g g_d1 g_d11 g_d12 g_d2 g_d22 t y0 a0 b bu th thu v0 := by
  refine ⟨?_, ?_, ?_, ?_, ?_, ?_, ?_, ?_⟩ <;> simp only [Gen.adj_fgp_s_scalar_11_en_f_0_0, Gen.adj_f_s_scalar_11_en_out_0_0, Gen.adj_fgp_s_scalar_11_en_f_0_1, Gen.adj_f_s_scalar_11_en_out_0_1, Gen.adj_fgp_s_scalar_11_en_f_0_2, Gen.adj_f_s_scalar_11_en_out_0_2, Gen.adj_fgp_s_scalar_11_en_f_0_3, Gen.adj_f_s_scalar_11_en_out_0_3, Gen.adj_fgp_s_scalar_11_en_gp_0_0, Gen.adj_gp_s_scalar_11_en_out_0_0, Gen.adj_fgp_s_scalar_11_en_gp_0_1, Gen.adj_gp_s_scalar_11_en_out_0_1, Gen.adj_fgp_s_scalar_11_en_gp_0_2, Gen.adj_gp_s_scalar_11_en_out_0_2, Gen.adj_fgp_s_scalar_11_en_gp_0_3, Gen.adj_gp_s_scalar_11_en_out_0_3] <;> ring

theorem adj_fgp_s_scalar_11_en_graph (f : K → K → K → K) (f_d1 : K → K → K → K) (f_d2 : K → K → K → K) (g : K → K → K → K) (g_d1 : K → K → K → K) (g_d11 : K → K → K → K) (g_d12 : K → K → K → K) (g_d2 : K → K → K → K) (t y0 a0 b bu th thu v0 : K) :
    Gen.adj_fgp_s_scalar_11_en_rg_f f f_d1 f_d2 g g_d1 g_d2 t y0 a0 b bu th thu v0 = 1 ∧
    Gen.adj_fgp_s_scalar_11_en_leaf_f f f_d1 f_d2 g g_d1 g_d2 t y0 a0 b bu th thu v0 = 0 ∧
    Gen.adj_fgp_s_scalar_11_en_rg_gp f f_d1 f_d2 g g_d1 g_d2 t y0 a0 b bu th thu v0 = 1 ∧
    Gen.adj_fgp_s_scalar_11_en_leaf_gp f f_d1 f_d2 g g_d1 g_d2 t y0 a0 b bu th thu v0 = 0 ∧
    Gen.adj_fgp_s_scalar_11_en_rg_z_after f f_d1 f_d2 g g_d1 g_d2 t y0 a0 b bu th thu v0 = 1 ∧
    Gen.adj_fgp_s_scalar_11_en_leaf_z_after f f_d1 f_d2 g g_d1 g_d2 t y0 a0 b bu th thu v0 = 1 := by
  refine ⟨?_, ?_, ?_, ?_, ?_, ?_⟩ <;> simp only [Gen.adj_fgp_s_scalar_11_en_rg_f, Gen.adj_fgp_s_scalar_11_en_leaf_f, Gen.adj_fgp_s_scalar_11_en_rg_gp, Gen.adj_fgp_s_scalar_11_en_leaf_gp, Gen.adj_fgp_s_scalar_11_en_rg_z_after, Gen.adj_fgp_s_scalar_11_en_leaf_z_after]

theorem adj_f_s_scalar_21_ng_spec (f0 : K → K → K → K → K) (f0_d1 : K → K → K → K → K) (f0_d2 : K → K → K → K → K) (f0_d3 : K → K → K → K → K) (f1 : K → K → K → K → K) (f1_d1 : K → K → K → K → K) (f1_d2 : K → K → K → K → K) (f1_d3 : K → K → K → K → K) (g00 : K → K → K → K → K) (g00_d1 : K → K → K → K → K) (g00_d11 : K → K → K → K → K) (g00_d12 : K → K → K → K → K) (g00_d13 : K → K → K → K → K) (g00_d2 : K → K → K → K → K) (g00_d22 : K → K → K → K → K) (g00_d23 : K → K → K → K → K) (g00_d3 : K → K → K → K → K) (g10 : K → K → K → K → K) (g10_d1 : K → K → K → K → K) (g10_d11 : K → K → K → K → K) (g10_d12 : K → K → K → K → K) (g10_d13 : K → K → K → K → K) (g10_d2 : K → K → K → K → K) (g10_d22 : K → K → K → K → K) (g10_d23 : K → K → K → K → K) (g10_d3 : K → K → K → K → K) (t y0 y1 a0 a1 b bu th thu : K) :
    Gen.adj_f_s_scalar_21_ng_out_0_0 f0 f0_d1 f0_d2 f0_d3 f1 f1_d1 f1_d2 f1_d3 t y0 y1 a0 a1 b bu th thu
      = stratDriftY (jet_scalar_21 f0 f0_d1 f0_d2 f0_d3 f1 f1_d1 f1_d2 f1_d3 g00 g00_d1 g00_d11 g00_d12 g00_d13 g00_d2 g00_d22 g00_d23 g00_d3 g10 g10_d1 g10_d11 g10_d12 g10_d13 g10_d2 g10_d22 g10_d23 g10_d3 t y0 y1 th) 0 ∧
    Gen.adj_f_s_scalar_21_ng_out_0_1 f0 f0_d1 f0_d2 f0_d3 f1 f1_d1 f1_d2 f1_d3 t y0 y1 a0 a1 b bu th thu
      = stratDriftY (jet_scalar_21 f0 f0_d1 f0_d2 f0_d3 f1 f1_d1 f1_d2 f1_d3 g00 g00_d1 g00_d11 g00_d12 g00_d13 g00_d2 g00_d22 g00_d23 g00_d3 g10 g10_d1 g10_d11 g10_d12 g10_d13 g10_d2 g10_d22 g10_d23 g10_d3 t y0 y1 th) 1 ∧
    Gen.adj_f_s_scalar_21_ng_out_0_2 f0 f0_d1 f0_d2 f0_d3 f1 f1_d1 f1_d2 f1_d3 t y0 y1 a0 a1 b bu th thu
      = stratDriftA (jet_scalar_21 f0 f0_d1 f0_d2 f0_d3 f1 f1_d1 f1_d2 f1_d3 g00 g00_d1 g00_d11 g00_d12 g00_d13 g00_d2 g00_d22 g00_d23 g00_d3 g10 g10_d1 g10_d11 g10_d12 g10_d13 g10_d2 g10_d22 g10_d23 g10_d3 t y0 y1 th) ![a0, a1] 0 ∧
    Gen.adj_f_s_scalar_21_ng_out_0_3 f0 f0_d1 f0_d2 f0_d3 f1 f1_d1 f1_d2 f1_d3 t y0 y1 a0 a1 b bu th thu
      = stratDriftA (jet_scalar_21 f0 f0_d1 f0_d2 f0_d3 f1 f1_d1 f1_d2 f1_d3 g00 g00_d1 g00_d11 g00_d12 g00_d13 g00_d2 g00_d22 g00_d23 g00_d3 g10 g10_d1 g10_d11 g10_d12 g10_d13 g10_d2 g10_d22 g10_d23 g10_d3 t y0 y1 th) ![a0, a1] 1 ∧
    Gen.adj_f_s_scalar_21_ng_out_0_4 f0 f0_d1 f0_d2 f0_d3 f1 f1_d1 f1_d2 f1_d3 t y0 y1 a0 a1 b bu th thu
      = stratDriftTh (jet_scalar_21 f0 f0_d1 f0_d2 f0_d3 f1 f1_d1 f1_d2 f1_d3 g00 g00_d1 g00_d11 g00_d12 g00_d13 g00_d2 g00_d22 g00_d23 g00_d3 g10 g10_d1 g10_d11 g10_d12 g10_d13 g10_d2 g10_d22 g10_d23 g10_d3 t y0 y1 th) ![a0, a1] 0 ∧
    Gen.adj_f_s_scalar_21_ng_out_0_5 f0 f0_d1 f0_d2 f0_d3 f1 f1_d1 f1_d2 f1_d3 t y0 y1 a0 a1 b bu th thu
      = stratDriftTh (jet_scalar_21 f0 f0_d1 f0_d2 f0_d3 f1 f1_d1 f1_d2 f1_d3 g00 g00_d1 g00_d11 g00_d12 g00_d13 g00_d2 g00_d22 g00_d23 g00_d3 g10 g10_d1 g10_d11 g10_d12 g10_d13 g10_d2 g10_d22 g10_d23 g10_d3 t y0 y1 th) ![a0, a1] 1 := by
  refine ⟨?_, ?_, ?_, ?_, ?_, ?_⟩ <;>
  simp [Gen.adj_f_s_scalar_21_ng_out_0_0, Gen.adj_f_s_scalar_21_ng_out_0_1, Gen.adj_f_s_scalar_21_ng_out_0_2, Gen.adj_f_s_scalar_21_ng_out_0_3, Gen.adj_f_s_scalar_21_ng_out_0_4, Gen.adj_f_s_scalar_21_ng_out_0_5, jet_scalar_21, stratDriftY, stratDriftA, stratDriftTh, itoDriftY, itoDriftA, itoDriftTh, gProdY, gProdA, gProdTh, gdgY, gdgA, gdgTh, driftY, driftA, driftTh, diffY, diffA, diffTh, itoCorr, itoCorrY, itoCorrTh, fStrat, fStratY, fStratTh, colCorrY, colCorrA, colCorrTh, Fin.sum_univ_two, Fin.sum_univ_one, Fin.isValue, Matrix.cons_val_zero, Matrix.cons_val_one, Matrix.cons_val_fin_one, Matrix.head_cons] <;> ring

theorem adj_f_s_scalar_21_ng_unused_param_zero (f0 : K → K → K → K → K) (f0_d1 : K → K → K → K → K) (f0_d2 : K → K → K → K → K) (f0_d3 : K → K → K → K → K) (f1 : K → K → K → K → K) (f1_d1 : K → K → K → K → K) (f1_d2 : K → K → K → K → K) (f1_d3 : K → K → K → K → K) (g00 : K → K → K → K → K) (g00_d1 : K → K → K → K → K) (g00_d11 : K → K → K → K → K) (g00_d12 : K → K → K → K → K) (g00_d13 : K → K → K → K → K) (g00_d2 : K → K → K → K → K) (g00_d22 : K → K → K → K → K) (g00_d23 : K → K → K → K → K) (g00_d3 : K → K → K → K → K) (g10 : K → K → K → K → K) (g10_d1 : K → K → K → K → K) (g10_d11 : K → K → K → K → K) (g10_d12 : K → K → K → K → K) (g10_d13 : K → K → K → K → K) (g10_d2 : K → K → K → K → K) (g10_d22 : K → K → K → K → K) (g10_d23 : K → K → K → K → K) (g10_d3 : K → K → K → K → K) (t y0 y1 a0 a1 b bu th thu : K) :
    Gen.adj_f_s_scalar_21_ng_out_0_5 f0 f0_d1 f0_d2 f0_d3 f1 f1_d1 f1_d2 f1_d3 t y0 y1 a0 a1 b bu th thu = 0 := by
  simp [Gen.adj_f_s_scalar_21_ng_out_0_5]

theorem adj_f_s_scalar_21_ng_graph (f0 : K → K → K → K → K) (f0_d1 : K → K → K → K → K) (f0_d2 : K → K → K → K → K) (f0_d3 : K → K → K → K → K) (f1 : K → K → K → K → K) (f1_d1 : K → K → K → K → K) (f1_d2 : K → K → K → K → K) (f1_d3 : K → K → K → K → K) (g00 : K → K → K → K → K) (g00_d1 : K → K → K → K → K) (g00_d11 : K → K → K → K → K) (g00_d12 : K → K → K → K → K) (g00_d13 : K → K → K → K → K) (g00_d2 : K → K → K → K → K) (g00_d22 : K → K → K → K → K) (g00_d23 : K → K → K → K → K) (g00_d3 : K → K → K → K → K) (g10 : K → K → K → K → K) (g10_d1 : K → K → K → K → K) (g10_d11 : K → K → K → K → K) (g10_d12 : K → K → K → K → K) (g10_d13 : K → K → K → K → K) (g10_d2 : K → K → K → K → K) (g10_d22 : K → K → K → K → K) (g10_d23 : K → K → K → K → K) (g10_d3 : K → K → K → K → K) (t y0 y1 a0 a1 b bu th thu : K) :
    Gen.adj_f_s_scalar_21_ng_rg_out f0 f0_d1 f0_d2 f0_d3 f1 f1_d1 f1_d2 f1_d3 t y0 y1 a0 a1 b bu th thu = 0 ∧
    Gen.adj_f_s_scalar_21_ng_leaf_out f0 f0_d1 f0_d2 f0_d3 f1 f1_d1 f1_d2 f1_d3 t y0 y1 a0 a1 b bu th thu = 1 ∧
    Gen.adj_f_s_scalar_21_ng_rg_z_after f0 f0_d1 f0_d2 f0_d3 f1 f1_d1 f1_d2 f1_d3 t y0 y1 a0 a1 b bu th thu = 0 ∧
    Gen.adj_f_s_scalar_21_ng_leaf_z_after f0 f0_d1 f0_d2 f0_d3 f1 f1_d1 f1_d2 f1_d3 t y0 y1 a0 a1 b bu th thu = 1 := by
  refine ⟨?_, ?_, ?_, ?_⟩ <;> simp only [Gen.adj_f_s_scalar_21_ng_rg_out, Gen.adj_f_s_scalar_21_ng_leaf_out, Gen.adj_f_s_scalar_21_ng_rg_z_after, Gen.adj_f_s_scalar_21_ng_leaf_z_after]

theorem adj_f_s_scalar_21_en_spec (f0 : K → K → K → K → K) (f0_d1 : K → K → K → K → K) (f0_d2 : K → K → K → K → K) (f0_d3 : K → K → K → K → K) (f1 : K → K → K → K → K) (f1_d1 : K → K → K → K → K) (f1_d2 : K → K → K → K → K) (f1_d3 : K → K → K → K → K) (g00 : K → K → K → K → K) (g00_d1 : K → K → K → K → K) (g00_d11 : K → K → K → K → K) (g00_d12 : K → K → K → K → K) (g00_d13 : K → K → K → K → K) (g00_d2 : K → K → K → K → K) (g00_d22 : K → K → K → K → K) (g00_d23 : K → K → K → K → K) (g00_d3 : K → K → K → K → K) (g10 : K → K → K → K → K) (g10_d1 : K → K → K → K → K) (g10_d11 : K → K → K → K → K) (g10_d12 : K → K → K → K → K) (g10_d13 : K → K → K → K → K) (g10_d2 : K → K → K → K → K) (g10_d22 : K → K → K → K → K) (g10_d23 : K → K → K → K → K) (g10_d3 : K → K → K → K → K) (t y0 y1 a0 a1 b bu th thu : K) :
    Gen.adj_f_s_scalar_21_en_out_0_0 f0 f0_d1 f0_d2 f0_d3 f1 f1_d1 f1_d2 f1_d3 t y0 y1 a0 a1 b bu th thu
      = stratDriftY (jet_scalar_21 f0 f0_d1 f0_d2 f0_d3 f1 f1_d1 f1_d2 f1_d3 g00 g00_d1 g00_d11 g00_d12 g00_d13 g00_d2 g00_d22 g00_d23 g00_d3 g10 g10_d1 g10_d11 g10_d12 g10_d13 g10_d2 g10_d22 g10_d23 g10_d3 t y0 y1 th) 0 ∧
    Gen.adj_f_s_scalar_21_en_out_0_1 f0 f0_d1 f0_d2 f0_d3 f1 f1_d1 f1_d2 f1_d3 t y0 y1 a0 a1 b bu th thu
      = stratDriftY (jet_scalar_21 f0 f0_d1 f0_d2 f0_d3 f1 f1_d1 f1_d2 f1_d3 g00 g00_d1 g00_d11 g00_d12 g00_d13 g00_d2 g00_d22 g00_d23 g00_d3 g10 g10_d1 g10_d11 g10_d12 g10_d13 g10_d2 g10_d22 g10_d23 g10_d3 t y0 y1 th) 1 ∧
    Gen.adj_f_s_scalar_21_en_out_0_2 f0 f0_d1 f0_d2 f0_d3 f1 f1_d1 f1_d2 f1_d3 t y0 y1 a0 a1 b bu th thu
      = stratDriftA (jet_scalar_21 f0 f0_d1 f0_d2 f0_d3 f1 f1_d1 f1_d2 f1_d3 g00 g00_d1 g00_d11 g00_d12 g00_d13 g00_d2 g00_d22 g00_d23 g00_d3 g10 g10_d1 g10_d11 g10_d12 g10_d13 g10_d2 g10_d22 g10_d23 g10_d3 t y0 y1 th) ![a0, a1] 0 ∧
    Gen.adj_f_s_scalar_21_en_out_0_3 f0 f0_d1 f0_d2 f0_d3 f1 f1_d1 f1_d2 f1_d3 t y0 y1 a0 a1 b bu th thu
      = stratDriftA (jet_scalar_21 f0 f0_d1 f0_d2 f0_d3 f1 f1_d1 f1_d2 f1_d3 g00 g00_d1 g00_d11 g00_d12 g00_d13 g00_d2 g00_d22 g00_d23 g00_d3 g10 g10_d1 g10_d11 g10_d12 g10_d13 g10_d2 g10_d22 g10_d23 g10_d3 t y0 y1 th) ![a0, a1] 1 ∧
    Gen.adj_f_s_scalar_21_en_out_0_4 f0 f0_d1 f0_d2 f0_d3 f1 f1_d1 f1_d2 f1_d3 t y0 y1 a0 a1 b bu th thu
      = stratDriftTh (jet_scalar_21 f0 f0_d1 f0_d2 f0_d3 f1 f1_d1 f1_d2 f1_d3 g00 g00_d1 g00_d11 g00_d12 g00_d13 g00_d2 g00_d22 g00_d23 g00_d3 g10 g10_d1 g10_d11 g10_d12 g10_d13 g10_d2 g10_d22 g10_d23 g10_d3 t y0 y1 th) ![a0, a1] 0 ∧
    Gen.adj_f_s_scalar_21_en_out_0_5 f0 f0_d1 f0_d2 f0_d3 f1 f1_d1 f1_d2 f1_d3 t y0 y1 a0 a1 b bu th thu
      = stratDriftTh (jet_scalar_21 f0 f0_d1 f0_d2 f0_d3 f1 f1_d1 f1_d2 f1_d3 g00 g00_d1 g00_d11 g00_d12 g00_d13 g00_d2 g00_d22 g00_d23 g00_d3 g10 g10_d1 g10_d11 g10_d12 g10_d13 g10_d2 g10_d22 g10_d23 g10_d3 t y0 y1 th) ![a0, a1] 1 := by
  refine ⟨?_, ?_, ?_, ?_, ?_, ?_⟩ <;>
  simp [Gen.adj_f_s_scalar_21_en_out_0_0, Gen.adj_f_s_scalar_21_en_out_0_1, Gen.adj_f_s_scalar_21_en_out_0_2, Gen.adj_f_s_scalar_21_en_out_0_3, Gen.adj_f_s_scalar_21_en_out_0_4, Gen.adj_f_s_scalar_21_en_out_0_5, jet_scalar_21, stratDriftY, stratDriftA, stratDriftTh, itoDriftY, itoDriftA, itoDriftTh, gProdY, gProdA, gProdTh, gdgY, gdgA, gdgTh, driftY, driftA, driftTh, diffY, diffA, diffTh, itoCorr, itoCorrY, itoCorrTh, fStrat, fStratY, fStratTh, colCorrY, colCorrA, colCorrTh, Fin.sum_univ_two, Fin.sum_univ_one, Fin.isValue, Matrix.cons_val_zero, Matrix.cons_val_one, Matrix.cons_val_fin_one, Matrix.head_cons] <;> ring

theorem adj_f_s_scalar_21_en_unused_param_zero (f0 : K → K → K → K → K) (f0_d1 : K → K → K → K → K) (f0_d2 : K → K → K → K → K) (f0_d3 : K → K → K → K → K) (f1 : K → K → K → K → K) (f1_d1 : K → K → K → K → K) (f1_d2 : K → K → K → K → K) (f1_d3 : K → K → K → K → K) (g00 : K → K → K → K → K) (g00_d1 : K → K → K → K → K) (g00_d11 : K → K → K → K → K) (g00_d12 : K → K → K → K → K) (g00_d13 : K → K → K → K → K) (g00_d2 : K → K → K → K → K) (g00_d22 : K → K → K → K → K) (g00_d23 : K → K → K → K → K) (g00_d3 : K → K → K → K → K) (g10 : K → K → K → K → K) (g10_d1 : K → K → K → K → K) (g10_d11 : K → K → K → K → K) (g10_d12 : K → K → K → K → K) (g10_d13 : K → K → K → K → K) (g10_d2 : K → K → K → K → K) (g10_d22 : K → K → K → K → K) (g10_d23 : K → K → K → K → K) (g10_d3 : K → K → K → K → K) (t y0 y1 a0 a1 b bu th thu : K) :
    Gen.adj_f_s_scalar_21_en_out_0_5 f0 f0_d1 f0_d2 f0_d3 f1 f1_d1 f1_d2 f1_d3 t y0 y1 a0 a1 b bu th thu = 0 := by
  simp [Gen.adj_f_s_scalar_21_en_out_0_5]

theorem adj_f_s_scalar_21_en_graph (f0 : K → K → K → K → K) (f0_d1 : K → K → K → K → K) (f0_d2 : K → K → K → K → K) (f0_d3 : K → K → K → K → K) (f1 : K → K → K → K → K) (f1_d1 : K → K → K → K → K) (f1_d2 : K → K → K → K → K) (f1_d3 : K → K → K → K → K) (g00 : K → K → K → K → K) (g00_d1 : K → K → K → K → K) (g00_d11 : K → K → K → K → K) (g00_d12 : K → K → K → K → K) (g00_d13 : K → K → K → K → K) (g00_d2 : K → K → K → K → K) (g00_d22 : K → K → K → K → K) (g00_d23 : K → K → K → K → K) (g00_d3 : K → K → K → K → K) (g10 : K → K → K → K → K) (g10_d1 : K → K → K → K → K) (g10_d11 : K → K → K → K → K) (g10_d12 : K → K → K → K → K) (g10_d13 : K → K → K → K → K) (g10_d2 : K → K → K → K → K) (g10_d22 : K → K → K → K → K) (g10_d23 : K → K → K → K → K) (g10_d3 : K → K → K → K → K) (t y0 y1 a0 a1 b bu th thu : K) :
    Gen.adj_f_s_scalar_21_en_rg_out f0 f0_d1 f0_d2 f0_d3 f1 f1_d1 f1_d2 f1_d3 t y0 y1 a0 a1 b bu th thu = 1 ∧
    Gen.adj_f_s_scalar_21_en_leaf_out f0 f0_d1 f0_d2 f0_d3 f1 f1_d1 f1_d2 f1_d3 t y0 y1 a0 a1 b bu th thu = 0 ∧
    Gen.adj_f_s_scalar_21_en_rg_z_after f0 f0_d1 f0_d2 f0_d3 f1 f1_d1 f1_d2 f1_d3 t y0 y1 a0 a1 b bu th thu = 1 ∧
    Gen.adj_f_s_scalar_21_en_leaf_z_after f0 f0_d1 f0_d2 f0_d3 f1 f1_d1 f1_d2 f1_d3 t y0 y1 a0 a1 b bu th thu = 1 := by
  refine ⟨?_, ?_, ?_, ?_⟩ <;> simp only [Gen.adj_f_s_scalar_21_en_rg_out, Gen.adj_f_s_scalar_21_en_leaf_out, Gen.adj_f_s_scalar_21_en_rg_z_after, Gen.adj_f_s_scalar_21_en_leaf_z_after]

theorem adj_gp_s_scalar_21_ng_spec (f0 : K → K → K → K → K) (f0_d1 : K → K → K → K → K) (f0_d2 : K → K → K → K → K) (f0_d3 : K → K → K → K → K) (f1 : K → K → K → K → K) (f1_d1 : K → K → K → K → K) (f1_d2 : K → K → K → K → K) (f1_d3 : K → K → K → K → K) (g00 : K → K → K → K → K) (g00_d1 : K → K → K → K → K) (g00_d11 : K → K → K → K → K) (g00_d12 : K → K → K → K → K) (g00_d13 : K → K → K → K → K) (g00_d2 : K → K → K → K → K) (g00_d22 : K → K → K → K → K) (g00_d23 : K → K → K → K → K) (g00_d3 : K → K → K → K → K) (g10 : K → K → K → K → K) (g10_d1 : K → K → K → K → K) (g10_d11 : K → K → K → K → K) (g10_d12 : K → K → K → K → K) (g10_d13 : K → K → K → K → K) (g10_d2 : K → K → K → K → K) (g10_d22 : K → K → K → K → K) (g10_d23 : K → K → K → K → K) (g10_d3 : K → K → K → K → K) (t y0 y1 a0 a1 b bu th thu v0 : K) :
    Gen.adj_gp_s_scalar_21_ng_out_0_0 g00 g00_d1 g00_d2 g00_d3 g10 g10_d1 g10_d2 g10_d3 t y0 y1 a0 a1 b bu th thu v0
      = gProdY (jet_scalar_21 f0 f0_d1 f0_d2 f0_d3 f1 f1_d1 f1_d2 f1_d3 g00 g00_d1 g00_d11 g00_d12 g00_d13 g00_d2 g00_d22 g00_d23 g00_d3 g10 g10_d1 g10_d11 g10_d12 g10_d13 g10_d2 g10_d22 g10_d23 g10_d3 t y0 y1 th) ![v0] 0 ∧
    Gen.adj_gp_s_scalar_21_ng_out_0_1 g00 g00_d1 g00_d2 g00_d3 g10 g10_d1 g10_d2 g10_d3 t y0 y1 a0 a1 b bu th thu v0
      = gProdY (jet_scalar_21 f0 f0_d1 f0_d2 f0_d3 f1 f1_d1 f1_d2 f1_d3 g00 g00_d1 g00_d11 g00_d12 g00_d13 g00_d2 g00_d22 g00_d23 g00_d3 g10 g10_d1 g10_d11 g10_d12 g10_d13 g10_d2 g10_d22 g10_d23 g10_d3 t y0 y1 th) ![v0] 1 ∧
    Gen.adj_gp_s_scalar_21_ng_out_0_2 g00 g00_d1 g00_d2 g00_d3 g10 g10_d1 g10_d2 g10_d3 t y0 y1 a0 a1 b bu th thu v0
      = gProdA (jet_scalar_21 f0 f0_d1 f0_d2 f0_d3 f1 f1_d1 f1_d2 f1_d3 g00 g00_d1 g00_d11 g00_d12 g00_d13 g00_d2 g00_d22 g00_d23 g00_d3 g10 g10_d1 g10_d11 g10_d12 g10_d13 g10_d2 g10_d22 g10_d23 g10_d3 t y0 y1 th) ![a0, a1] ![v0] 0 ∧
    Gen.adj_gp_s_scalar_21_ng_out_0_3 g00 g00_d1 g00_d2 g00_d3 g10 g10_d1 g10_d2 g10_d3 t y0 y1 a0 a1 b bu th thu v0
      = gProdA (jet_scalar_21 f0 f0_d1 f0_d2 f0_d3 f1 f1_d1 f1_d2 f1_d3 g00 g00_d1 g00_d11 g00_d12 g00_d13 g00_d2 g00_d22 g00_d23 g00_d3 g10 g10_d1 g10_d11 g10_d12 g10_d13 g10_d2 g10_d22 g10_d23 g10_d3 t y0 y1 th) ![a0, a1] ![v0] 1 ∧
    Gen.adj_gp_s_scalar_21_ng_out_0_4 g00 g00_d1 g00_d2 g00_d3 g10 g10_d1 g10_d2 g10_d3 t y0 y1 a0 a1 b bu th thu v0
      = gProdTh (jet_scalar_21 f0 f0_d1 f0_d2 f0_d3 f1 f1_d1 f1_d2 f1_d3 g00 g00_d1 g00_d11 g00_d12 g00_d13 g00_d2 g00_d22 g00_d23 g00_d3 g10 g10_d1 g10_d11 g10_d12 g10_d13 g10_d2 g10_d22 g10_d23 g10_d3 t y0 y1 th) ![a0, a1] ![v0] 0 ∧
    Gen.adj_gp_s_scalar_21_ng_out_0_5 g00 g00_d1 g00_d2 g00_d3 g10 g10_d1 g10_d2 g10_d3 t y0 y1 a0 a1 b bu th thu v0
      = gProdTh (jet_scalar_21 f0 f0_d1 f0_d2 f0_d3 f1 f1_d1 f1_d2 f1_d3 g00 g00_d1 g00_d11 g00_d12 g00_d13 g00_d2 g00_d22 g00_d23 g00_d3 g10 g10_d1 g10_d11 g10_d12 g10_d13 g10_d2 g10_d22 g10_d23 g10_d3 t y0 y1 th) ![a0, a1] ![v0] 1 := by
  refine ⟨?_, ?_, ?_, ?_, ?_, ?_⟩ <;>
  simp [Gen.adj_gp_s_scalar_21_ng_out_0_0, Gen.adj_gp_s_scalar_21_ng_out_0_1, Gen.adj_gp_s_scalar_21_ng_out_0_2, Gen.adj_gp_s_scalar_21_ng_out_0_3, Gen.adj_gp_s_scalar_21_ng_out_0_4, Gen.adj_gp_s_scalar_21_ng_out_0_5, jet_scalar_21, stratDriftY, stratDriftA, stratDriftTh, itoDriftY, itoDriftA, itoDriftTh, gProdY, gProdA, gProdTh, gdgY, gdgA, gdgTh, driftY, driftA, driftTh, diffY, diffA, diffTh, itoCorr, itoCorrY, itoCorrTh, fStrat, fStratY, fStratTh, colCorrY, colCorrA, colCorrTh, Fin.sum_univ_two, Fin.sum_univ_one, Fin.isValue, Matrix.cons_val_zero, Matrix.cons_val_one, Matrix.cons_val_fin_one, Matrix.head_cons] <;> ring

theorem adj_gp_s_scalar_21_ng_unused_param_zero (f0 : K → K → K → K → K) (f0_d1 : K → K → K → K → K) (f0_d2 : K → K → K → K → K) (f0_d3 : K → K → K → K → K) (f1 : K → K → K → K → K) (f1_d1 : K → K → K → K → K) (f1_d2 : K → K → K → K → K) (f1_d3 : K → K → K → K → K) (g00 : K → K → K → K → K) (g00_d1 : K → K → K → K → K) (g00_d11 : K → K → K → K → K) (g00_d12 : K → K → K → K → K) (g00_d13 : K → K → K → K → K) (g00_d2 : K → K → K → K → K) (g00_d22 : K → K → K → K → K) (g00_d23 : K → K → K → K → K) (g00_d3 : K → K → K → K → K) (g10 : K → K → K → K → K) (g10_d1 : K → K → K → K → K) (g10_d11 : K → K → K → K → K) (g10_d12 : K → K → K → K → K) (g10_d13 : K → K → K → K → K) (g10_d2 : K → K → K → K → K) (g10_d22 : K → K → K → K → K) (g10_d23 : K → K → K → K → K) (g10_d3 : K → K → K → K → K) (t y0 y1 a0 a1 b bu th thu v0 : K) :
    Gen.adj_gp_s_scalar_21_ng_out_0_5 g00 g00_d1 g00_d2 g00_d3 g10 g10_d1 g10_d2 g10_d3 t y0 y1 a0 a1 b bu th thu v0 = 0 := by
  simp [Gen.adj_gp_s_scalar_21_ng_out_0_5]

theorem adj_gp_s_scalar_21_ng_graph (f0 : K → K → K → K → K) (f0_d1 : K → K → K → K → K) (f0_d2 : K → K → K → K → K) (f0_d3 : K → K → K → K → K) (f1 : K → K → K → K → K) (f1_d1 : K → K → K → K → K) (f1_d2 : K → K → K → K → K) (f1_d3 : K → K → K → K → K) (g00 : K → K → K → K → K) (g00_d1 : K → K → K → K → K) (g00_d11 : K → K → K → K → K) (g00_d12 : K → K → K → K → K) (g00_d13 : K → K → K → K → K) (g00_d2 : K → K → K → K → K) (g00_d22 : K → K → K → K → K) (g00_d23 : K → K → K → K → K) (g00_d3 : K → K → K → K → K) (g10 : K → K → K → K → K) (g10_d1 : K → K → K → K → K) (g10_d11 : K → K → K → K → K) (g10_d12 : K → K → K → K → K) (g10_d13 : K → K → K → K → K) (g10_d2 : K → K → K → K → K) (g10_d22 : K → K → K → K → K) (g10_d23 : K → K → K → K → K) (g10_d3 : K → K → K → K → K) (t y0 y1 a0 a1 b bu th thu v0 : K) :
    Gen.adj_gp_s_scalar_21_ng_rg_out g00 g00_d1 g00_d2 g00_d3 g10 g10_d1 g10_d2 g10_d3 t y0 y1 a0 a1 b bu th thu v0 = 0 ∧
    Gen.adj_gp_s_scalar_21_ng_leaf_out g00 g00_d1 g00_d2 g00_d3 g10 g10_d1 g10_d2 g10_d3 t y0 y1 a0 a1 b bu th thu v0 = 1 ∧
    Gen.adj_gp_s_scalar_21_ng_rg_z_after g00 g00_d1 g00_d2 g00_d3 g10 g10_d1 g10_d2 g10_d3 t y0 y1 a0 a1 b bu th thu v0 = 0 ∧
    Gen.adj_gp_s_scalar_21_ng_leaf_z_after g00 g00_d1 g00_d2 g00_d3 g10 g10_d1 g10_d2 g10_d3 t y0 y1 a0 a1 b bu th thu v0 = 1 := by
  refine ⟨?_, ?_, ?_, ?_⟩ <;> simp only [Gen.adj_gp_s_scalar_21_ng_rg_out, Gen.adj_gp_s_scalar_21_ng_leaf_out, Gen.adj_gp_s_scalar_21_ng_rg_z_after, Gen.adj_gp_s_scalar_21_ng_leaf_z_after]

theorem adj_gp_s_scalar_21_en_spec (f0 : K → K → K → K → K) (f0_d1 : K → K → K → K → K) (f0_d2 : K → K → K → K → K) (f0_d3 : K → K → K → K → K) (f1 : K → K → K → K → K) (f1_d1 : K → K → K → K → K) (f1_d2 : K → K → K → K → K) (f1_d3 : K → K → K → K → K) (g00 : K → K → K → K → K) (g00_d1 : K → K → K → K → K) (g00_d11 : K → K → K → K → K) (g00_d12 : K → K → K → K → K) (g00_d13 : K → K → K → K → K) (g00_d2 : K → K → K → K → K) (g00_d22 : K → K → K → K → K) (g00_d23 : K → K → K → K → K) (g00_d3 : K → K → K → K → K) (g10 : K → K → K → K → K) (g10_d1 : K → K → K → K → K) (g10_d11 : K → K → K → K → K) (g10_d12 : K → K → K → K → K) (g10_d13 : K → K → K → K → K) (g10_d2 : K → K → K → K → K) (g10_d22 : K → K → K → K → K) (g10_d23 : K → K → K → K → K) (g10_d3 : K → K → K → K → K) (t y0 y1 a0 a1 b bu th thu v0 : K) :
    Gen.adj_gp_s_scalar_21_en_out_0_0 g00 g00_d1 g00_d2 g00_d3 g10 g10_d1 g10_d2 g10_d3 t y0 y1 a0 a1 b bu th thu v0
      = gProdY (jet_scalar_21 f0 f0_d1 f0_d2 f0_d3 f1 f1_d1 f1_d2 f1_d3 g00 g00_d1 g00_d11 g00_d12 g00_d13 g00_d2 g00_d22 g00_d23 g00_d3 g10 g10_d1 g10_d11 g10_d12 g10_d13 g10_d2 g10_d22 g10_d23 g10_d3 t y0 y1 th) ![v0] 0 ∧
    Gen.adj_gp_s_scalar_21_en_out_0_1 g00 g00_d1 g00_d2 g00_d3 g10 g10_d1 g10_d2 g10_d3 t y0 y1 a0 a1 b bu th thu v0
      = gProdY (jet_scalar_21 f0 f0_d1 f0_d2 f0_d3 f1 f1_d1 f1_d2 f1_d3 g00 g00_d1 g00_d11 g00_d12 g00_d13 g00_d2 g00_d22 g00_d23 g00_d3 g10 g10_d1 g10_d11 g10_d12 g10_d13 g10_d2 g10_d22 g10_d23 g10_d3 t y0 y1 th) ![v0] 1 ∧
    Gen.adj_gp_s_scalar_21_en_out_0_2 g00 g00_d1 g00_d2 g00_d3 g10 g10_d1 g10_d2 g10_d3 t y0 y1 a0 a1 b bu th thu v0
      = gProdA (jet_scalar_21 f0 f0_d1 f0_d2 f0_d3 f1 f1_d1 f1_d2 f1_d3 g00 g00_d1 g00_d11 g00_d12 g00_d13 g00_d2 g00_d22 g00_d23 g00_d3 g10 g10_d1 g10_d11 g10_d12 g10_d13 g10_d2 g10_d22 g10_d23 g10_d3 t y0 y1 th) ![a0, a1] ![v0] 0 ∧
    Gen.adj_gp_s_scalar_21_en_out_0_3 g00 g00_d1 g00_d2 g00_d3 g10 g10_d1 g10_d2 g10_d3 t y0 y1 a0 a1 b bu th thu v0
      = gProdA (jet_scalar_21 f0 f0_d1 f0_d2 f0_d3 f1 f1_d1 f1_d2 f1_d3 g00 g00_d1 g00_d11 g00_d12 g00_d13 g00_d2 g00_d22 g00_d23 g00_d3 g10 g10_d1 g10_d11 g10_d12 g10_d13 g10_d2 g10_d22 g10_d23 g10_d3 t y0 y1 th) ![a0, a1] ![v0] 1 ∧
    Gen.adj_gp_s_scalar_21_en_out_0_4 g00 g00_d1 g00_d2 g00_d3 g10 g10_d1 g10_d2 g10_d3 t y0 y1 a0 a1 b bu th thu v0
      = gProdTh (jet_scalar_21 f0 f0_d1 f0_d2 f0_d3 f1 f1_d1 f1_d2 f1_d3 g00 g00_d1 g00_d11 g00_d12 g00_d13 g00_d2 g00_d22 g00_d23 g00_d3 g10 g10_d1 g10_d11 g10_d12 g10_d13 g10_d2 g10_d22 g10_d23 g10_d3 t y0 y1 th) ![a0, a1] ![v0] 0 ∧
    Gen.adj_gp_s_scalar_21_en_out_0_5 g00 g00_d1 g00_d2 g00_d3 g10 g10_d1 g10_d2 g10_d3 t y0 y1 a0 a1 b bu th thu v0
      = gProdTh (jet_scalar_21 f0 f0_d1 f0_d2 f0_d3 f1 f1_d1 f1_d2 f1_d3 g00 g00_d1 g00_d11 g00_d12 g00_d13 g00_d2 g00_d22 g00_d23 g00_d3 g10 g10_d1 g10_d11 g10_d12 g10_d13 g10_d2 g10_d22 g10_d23 g10_d3 t y0 y1 th) ![a0, a1] ![v0] 1 := by
  refine ⟨?_, ?_, ?_, ?_, ?_, ?_⟩ <;>
  simp [Gen.adj_gp_s_scalar_21_en_out_0_0, Gen.adj_gp_s_scalar_21_en_out_0_1, Gen.adj_gp_s_scalar_21_en_out_0_2, Gen.adj_gp_s_scalar_21_en_out_0_3, Gen.adj_gp_s_scalar_21_en_out_0_4, Gen.adj_gp_s_scalar_21_en_out_0_5, jet_scalar_21, stratDriftY, stratDriftA, stratDriftTh, itoDriftY, itoDriftA, itoDriftTh, gProdY, gProdA, gProdTh, gdgY, gdgA, gdgTh, driftY, driftA, driftTh, diffY, diffA, diffTh, itoCorr, itoCorrY, itoCorrTh, fStrat, fStratY, fStratTh, colCorrY, colCorrA, colCorrTh, Fin.sum_univ_two, Fin.sum_univ_one, Fin.isValue, Matrix.cons_val_zero, Matrix.cons_val_one, Matrix.cons_val_fin_one, Matrix.head_cons] <;> ring

theorem adj_gp_s_scalar_21_en_unused_param_zero (f0 : K → K → K → K → K) (f0_d1 : K → K → K → K → K) (f0_d2 : K → K → K → K → K) (f0_d3 : K → K → K → K → K) (f1 : K → K → K → K → K) (f1_d1 : K → K → K → K → K) (f1_d2 : K → K → K → K → K) (f1_d3 : K → K → K → K → K) (g00 : K → K → K → K → K) (g00_d1 : K → K → K → K → K) (g00_d11 : K → K → K → K → K) (g00_d12 : K → K → K → K → K) (g00_d13 : K → K → K → K → K) (g00_d2 : K → K → K → K → K) (g00_d22 : K → K → K → K → K) (g00_d23 : K → K → K → K → K) (g00_d3 : K → K → K → K → K) (g10 : K → K → K → K → K) (g10_d1 : K → K → K → K → K) (g10_d11 : K → K → K → K → K) (g10_d12 : K → K → K → K → K) (g10_d13 : K → K → K → K → K) (g10_d2 : K → K → K → K → K) (g10_d22 : K → K → K → K → K) (g10_d23 : K → K → K → K → K) (g10_d3 : K → K → K → K → K) (t y0 y1 a0 a1 b bu th thu v0 : K) :
    Gen.adj_gp_s_scalar_21_en_out_0_5 g00 g00_d1 g00_d2 g00_d3 g10 g10_d1 g10_d2 g10_d3 t y0 y1 a0 a1 b bu th thu v0 = 0 := by
  simp [Gen.adj_gp_s_scalar_21_en_out_0_5]

theorem adj_gp_s_scalar_21_en_graph (f0 : K → K → K → K → K) (f0_d1 : K → K → K → K → K) (f0_d2 : K → K → K → K → K) (f0_d3 : K → K → K → K → K) (f1 : K → K → K → K → K) (f1_d1 : K → K → K → K → K) (f1_d2 : K → K → K → K → K) (f1_d3 : K → K → K → K → K) (g00 : K → K → K → K → K) (g00_d1 : K → K → K → K → K) (g00_d11 : K → K → K → K → K) (g00_d12 : K → K → K → K → K) (g00_d13 : K → K → K → K → K) (g00_d2 : K → K → K → K → K) (g00_d22 : K → K → K → K → K) (g00_d23 : K → K → K → K → K) (g00_d3 : K → K → K → K → K) (g10 : K → K → K → K → K) (g10_d1 : K → K → K → K → K) (g10_d11 : K → K → K → K → K) (g10_d12 : K → K → K → K → K) (g10_d13 : K → K → K → K → K) (g10_d2 : K → K → K → K → K) (g10_d22 : K → K → K → K → K) (g10_d23 : K → K → K → K → K) (g10_d3 : K → K → K → K → K) (t y0 y1 a0 a1 b bu th thu v0 : K) :
    Gen.adj_gp_s_scalar_21_en_rg_out g00 g00_d1 g00_d2 g00_d3 g10 g10_d1 g10_d2 g10_d3 t y0 y1 a0 a1 b bu th thu v0 = 1 ∧
    Gen.adj_gp_s_scalar_21_en_leaf_out g00 g00_d1 g00_d2 g00_d3 g10 g10_d1 g10_d2 g10_d3 t y0 y1 a0 a1 b bu th thu v0 = 0 ∧
    Gen.adj_gp_s_scalar_21_en_rg_z_after g00 g00_d1 g00_d2 g00_d3 g10 g10_d1 g10_d2 g10_d3 t y0 y1 a0 a1 b bu th thu v0 = 1 ∧
    Gen.adj_gp_s_scalar_21_en_leaf_z_after g00 g00_d1 g00_d2 g00_d3 g10 g10_d1 g10_d2 g10_d3 t y0 y1 a0 a1 b bu th thu v0 = 1 := by
  refine ⟨?_, ?_, ?_, ?_⟩ <;> simp only [Gen.adj_gp_s_scalar_21_en_rg_out, Gen.adj_gp_s_scalar_21_en_leaf_out, Gen.adj_gp_s_scalar_21_en_rg_z_after, Gen.adj_gp_s_scalar_21_en_leaf_z_after]

theorem adj_fgp_s_scalar_21_ng_unused_param_zero (f0 : K → K → K → K → K) (f0_d1 : K → K → K → K → K) (f0_d2 : K → K → K → K → K) (f0_d3 : K → K → K → K → K) (f1 : K → K → K → K → K) (f1_d1 : K → K → K → K → K) (f1_d2 : K → K → K → K → K) (f1_d3 : K → K → K → K → K) (g00 : K → K → K → K → K) (g00_d1 : K → K → K → K → K) (g00_d11 : K → K → K → K → K) (g00_d12 : K → K → K → K → K) (g00_d13 : K → K → K → K → K) (g00_d2 : K → K → K → K → K) (g00_d22 : K → K → K → K → K) (g00_d23 : K → K → K → K → K) (g00_d3 : K → K → K → K → K) (g10 : K → K → K → K → K) (g10_d1 : K → K → K → K → K) (g10_d11 : K → K → K → K → K) (g10_d12 : K → K → K → K → K) (g10_d13 : K → K → K → K → K) (g10_d2 : K → K → K → K → K) (g10_d22 : K → K → K → K → K) (g10_d23 : K → K → K → K → K) (g10_d3 : K → K → K → K → K) (t y0 y1 a0 a1 b bu th thu v0 : K) :
    Gen.adj_fgp_s_scalar_21_ng_f_0_5 f0 f0_d1 f0_d2 f0_d3 f1 f1_d1 f1_d2 f1_d3 g00 g00_d1 g00_d2 g00_d3 g10 g10_d1 g10_d2 g10_d3 t y0 y1 a0 a1 b bu th thu v0 = 0 ∧
    Gen.adj_fgp_s_scalar_21_ng_gp_0_5 f0 f0_d1 f0_d2 f0_d3 f1 f1_d1 f1_d2 f1_d3 g00 g00_d1 g00_d2 g00_d3 g10 g10_d1 g10_d2 g10_d3 t y0 y1 a0 a1 b bu th thu v0 = 0 := by
  refine ⟨?_, ?_⟩ <;> simp [Gen.adj_fgp_s_scalar_21_ng_f_0_5, Gen.adj_fgp_s_scalar_21_ng_gp_0_5]

theorem adj_fgp_s_scalar_21_ng_pair (f0 : K → K → K → K → K) (f0_d1 : K → K → K → K → K) (f0_d2 : K → K → K → K → K) (f0_d3 : K → K → K → K → K) (f1 : K → K → K → K → K) (f1_d1 : K → K → K → K → K) (f1_d2 : K → K → K → K → K) (f1_d3 : K → K → K → K → K) (g00 : K → K → K → K → K) (g00_d1 : K → K → K → K → K) (g00_d11 : K → K → K → K → K) (g00_d12 : K → K → K → K → K) (g00_d13 : K → K → K → K → K) (g00_d2 : K → K → K → K → K) (g00_d22 : K → K → K → K → K) (g00_d23 : K → K → K → K → K) (g00_d3 : K → K → K → K → K) (g10 : K → K → K → K → K) (g10_d1 : K → K → K → K → K) (g10_d11 : K → K → K → K → K) (g10_d12 : K → K → K → K → K) (g10_d13 : K → K → K → K → K) (g10_d2 : K → K → K → K → K) (g10_d22 : K → K → K → K → K) (g10_d23 : K → K → K → K → K) (g10_d3 : K → K → K → K → K) (t y0 y1 a0 a1 b bu th thu v0 : K) :
    Gen.adj_fgp_s_scalar_21_ng_f_0_0 f0 f0_d1 f0_d2 f0_d3 f1 f1_d1 f1_d2 f1_d3 g00 g00_d1 g00_d2 g00_d3 g10 g10_d1 g10_d2 g10_d3 t y0 y1 a0 a1 b bu th thu v0
      = Gen.adj_f_s_scalar_21_ng_out_0_0 f0 f0_d1 f0_d2 f0_d3 f1 f1_d1 f1_d2 f1_d3 t y0 y1 a0 a1 b bu th thu ∧
    Gen.adj_fgp_s_scalar_21_ng_f_0_1 f0 f0_d1 f0_d2 f0_d3 f1 f1_d1 f1_d2 f1_d3 g00 g00_d1 g00_d2 g00_d3 g10 g10_d1 g10_d2 g10_d3 t y0 y1 a0 a1 b bu th thu v0
      = Gen.adj_f_s_scalar_21_ng_out_0_1 f0 f0_d1 f0_d2 f0_d3 f1 f1_d1 f1_d2 f1_d3 t y0 y1 a0 a1 b bu th thu ∧
    Gen.adj_fgp_s_scalar_21_ng_f_0_2 f0 f0_d1 f0_d2 f0_d3 f1 f1_d1 f1_d2 f1_d3 g00 g00_d1 g00_d2 g00_d3 g10 g10_d1 g10_d2 g10_d3 t y0 y1 a0 a1 b bu th thu v0
      = Gen.adj_f_s_scalar_21_ng_out_0_2 f0 f0_d1 f0_d2 f0_d3 f1 f1_d1 f1_d2 f1_d3 t y0 y1 a0 a1 b bu th thu ∧
    Gen.adj_fgp_s_scalar_21_ng_f_0_3 f0 f0_d1 f0_d2 f0_d3 f1 f1_d1 f1_d2 f1_d3 g00 g00_d1 g00_d2 g00_d3 g10 g10_d1 g10_d2 g10_d3 t y0 y1 a0 a1 b bu th thu v0
      = Gen.adj_f_s_scalar_21_ng_out_0_3 f0 f0_d1 f0_d2 f0_d3 f1 f1_d1 f1_d2 f1_d3 t y0 y1 a0 a1 b bu th thu ∧
    Gen.adj_fgp_s_scalar_21_ng_f_0_4 f0 f0_d1 f0_d2 f0_d3 f1 f1_d1 f1_d2 f1_d3 g00 g00_d1 g00_d2 g00_d3 g10 g10_d1 g10_d2 g10_d3 t y0 y1 a0 a1 b bu th thu v0
      = Gen.adj_f_s_scalar_21_ng_out_0_4 f0 f0_d1 f0_d2 f0_d3 f1 f1_d1 f1_d2 f1_d3 t y0 y1 a0 a1 b bu th thu ∧
    Gen.adj_fgp_s_scalar_21_ng_f_0_5 f0 f0_d1 f0_d2 f0_d3 f1 f1_d1 f1_d2 f1_d3 g00 g00_d1 g00_d2 g00_d3 g10 g10_d1 g10_d2 g10_d3 t y0 y1 a0 a1 b bu th thu v0
      = Gen.adj_f_s_scalar_21_ng_out_0_5 f0 f0_d1 f0_d2 f0_d3 f1 f1_d1 f1_d2 f1_d3 t y0 y1 a0 a1 b bu th thu ∧
    Gen.adj_fgp_s_scalar_21_ng_gp_0_0 f0 f0_d1 f0_d2 f0_d3 f1 f1_d1 f1_d2 f1_d3 g00 g00_d1 g00_d2 g00_d3 g10 g10_d1 g10_d2 g10_d3 t y0 y1 a0 a1 b bu th thu v0
      = Gen.adj_gp_s_scalar_21_ng_out_0_0 g00 g00_d1 g00_d2 g00_d3 g10 g10_d1 g10_d2 g10_d3 t y0 y1 a0 a1 b bu th thu v0 ∧
    Gen.adj_fgp_s_scalar_21_ng_gp_0_1 f0 f0_d1 f0_d2 f0_d3 f1 f1_d1 f1_d2 f1_d3 g00 g00_d1 g00_d2 g00_d3 g10 g10_d1 g10_d2 g10_d3 t y0 y1 a0 a1 b bu th thu v0
      = Gen.adj_gp_s_scalar_21_ng_out_0_1 g00 g00_d1 g00_d2 g00_d3 g10 g10_d1 g10_d2 g10_d3 t y0 y1 a0 a1 b bu th thu v0 ∧
    Gen.adj_fgp_s_scalar_21_ng_gp_0_2 f0 f0_d1 f0_d2 f0_d3 f1 f1_d1 f1_d2 f1_d3 g00 g00_d1 g00_d2 g00_d3 g10 g10_d1 g10_d2 g10_d3 t y0 y1 a0 a1 b bu th thu v0
      = Gen.adj_gp_s_scalar_21_ng_out_0_2 g00 g00_d1 g00_d2 g00_d3 g10 g10_d1 g10_d2 g10_d3 t y0 y1 a0 a1 b bu th thu v0 ∧
    Gen.adj_fgp_s_scalar_21_ng_gp_0_3 f0 f0_d1 f0_d2 f0_d3 f1 f1_d1 f1_d2 f1_d3 g00 g00_d1 g00_d2 g00_d3 g10 g10_d1 g10_d2 g10_d3 t y0 y1 a0 a1 b bu th thu v0
      = Gen.adj_gp_s_scalar_21_ng_out_0_3 g00 g00_d1 g00_d2 g00_d3 g10 g10_d1 g10_d2 g10_d3 t y0 y1 a0 a1 b bu th thu v0 ∧
    Gen.adj_fgp_s_scalar_21_ng_gp_0_4 f0 f0_d1 f0_d2 f0_d3 f1 f1_d1 f1_d2 f1_d3 g00 g00_d1 g00_d2 g00_d3 g10 g10_d1 g10_d2 g10_d3 t y0 y1 a0 a1 b bu th thu v0
      = Gen.adj_gp_s_scalar_21_ng_out_0_4 g00 g00_d1 g00_d2 g00_d3 g10 g10_d1 g10_d2 g10_d3 t y0 y1 a0 a1 b bu th thu v0 ∧
    Gen.adj_fgp_s_scalar_21_ng_gp_0_5 f0 f0_d1 f0_d2 f0_d3 f1 f1_d1 f1_d2 f1_d3 g00 g00_d1 g00_d2 g00_d3 g10 g10_d1 g10_d2 g10_d3 t y0 y1 a0 a1 b bu th thu v0
      = Gen.adj_gp_s_scalar_21_ng_out_0_5 g00 g00_d1 g00_d2 g00_d3 g10 g10_d1 g10_d2 g10_d3 t y0 y1 a0 a1 b bu th thu v0 := by
  refine ⟨?_, ?_, ?_, ?_, ?_, ?_, ?_, ?_, ?_, ?_, ?_, ?_⟩ <;> simp only [Gen.adj_fgp_s_scalar_21_ng_f_0_0, Gen.adj_f_s_scalar_21_ng_out_0_0, Gen.adj_fgp_s_scalar_21_ng_f_0_1, Gen.adj_f_s_scalar_21_ng_out_0_1, Gen.adj_fgp_s_scalar_21_ng_f_0_2, Gen.adj_f_s_scalar_21_ng_out_0_2, Gen.adj_fgp_s_scalar_21_ng_f_0_3, Gen.adj_f_s_scalar_21_ng_out_0_3, Gen.adj_fgp_s_scalar_21_ng_f_0_4, Gen.adj_f_s_scalar_21_ng_out_0_4, Gen.adj_fgp_s_scalar_21_ng_f_0_5, Gen.adj_f_s_scalar_21_ng_out_0_5, Gen.adj_fgp_s_scalar_21_ng_gp_0_0, Gen.adj_gp_s_scalar_21_ng_out_0_0, Gen.adj_fgp_s_scalar_21_ng_gp_0_1, Gen.adj_gp_s_scalar_21_ng_out_0_1, Gen.adj_fgp_s_scalar_21_ng_gp_0_2, Gen.adj_gp_s_scalar_21_ng_out_0_2, Gen.adj_fgp_s_scalar_21_ng_gp_0_3, Gen.adj_gp_s_scalar_21_ng_out_0_3, Gen.adj_fgp_s_scalar_21_ng_gp_0_4, Gen.adj_gp_s_scalar_21_ng_out_0_4, Gen.adj_fgp_s_scalar_21_ng_gp_0_5, Gen.adj_gp_s_scalar_21_ng_out_0_5] <;> ring

theorem adj_fgp_s_scalar_21_ng_graph (f0 : K → K → K → K → K) (f0_d1 : K → K → K → K → K) (f0_d2 : K → K → K → K → K) (f0_d3 : K → K → K → K → K) (f1 : K → K → K → K → K) (f1_d1 : K → K → K → K → K) (f1_d2 : K → K → K → K → K) (f1_d3 : K → K → K → K → K) (g00 : K → K → K → K → K) (g00_d1 : K → K → K → K → K) (g00_d11 : K → K → K → K → K) (g00_d12 : K → K → K → K → K) (g00_d13 : K → K → K → K → K) (g00_d2 : K → K → K → K → K) (g00_d22 : K → K → K → K → K) (g00_d23 : K → K → K → K → K) (g00_d3 : K → K → K → K → K) (g10 : K → K → K → K → K) (g10_d1 : K → K → K → K → K) (g10_d11 : K → K → K → K → K) (g10_d12 : K → K → K → K → K) (g10_d13 : K → K → K → K → K) (g10_d2 : K → K → K → K → K) (g10_d22 : K → K → K → K → K) (g10_d23 : K → K → K → K → K) (g10_d3 : K → K → K → K → K) (t y0 y1 a0 a1 b bu th thu v0 : K) :
    Gen.adj_fgp_s_scalar_21_ng_rg_f f0 f0_d1 f0_d2 f0_d3 f1 f1_d1 f1_d2 f1_d3 g00 g00_d1 g00_d2 g00_d3 g10 g10_d1 g10_d2 g10_d3 t y0 y1 a0 a1 b bu th thu v0 = 0 ∧
    Gen.adj_fgp_s_scalar_21_ng_leaf_f f0 f0_d1 f0_d2 f0_d3 f1 f1_d1 f1_d2 f1_d3 g00 g00_d1 g00_d2 g00_d3 g10 g10_d1 g10_d2 g10_d3 t y0 y1 a0 a1 b bu th thu v0 = 1 ∧
    Gen.adj_fgp_s_scalar_21_ng_rg_gp f0 f0_d1 f0_d2 f0_d3 f1 f1_d1 f1_d2 f1_d3 g00 g00_d1 g00_d2 g00_d3 g10 g10_d1 g10_d2 g10_d3 t y0 y1 a0 a1 b bu th thu v0 = 0 ∧
    Gen.adj_fgp_s_scalar_21_ng_leaf_gp f0 f0_d1 f0_d2 f0_d3 f1 f1_d1 f1_d2 f1_d3 g00 g00_d1 g00_d2 g00_d3 g10 g10_d1 g10_d2 g10_d3 t y0 y1 a0 a1 b bu th thu v0 = 1 ∧
    Gen.adj_fgp_s_scalar_21_ng_rg_z_after f0 f0_d1 f0_d2 f0_d3 f1 f1_d1 f1_d2 f1_d3 g00 g00_d1 g00_d2 g00_d3 g10 g10_d1 g10_d2 g10_d3 t y0 y1 a0 a1 b bu th thu v0 = 0 ∧
    Gen.adj_fgp_s_scalar_21_ng_leaf_z_after f0 f0_d1 f0_d2 f0_d3 f1 f1_d1 f1_d2 f1_d3 g00 g00_d1 g00_d2 g00_d3 g10 g10_d1 g10_d2 g10_d3 t y0 y1 a0 a1 b bu th thu v0 = 1 := by
  refine ⟨?_, ?_, ?_, ?_, ?_, ?_⟩ <;> simp only [Gen.adj_fgp_s_scalar_21_ng_rg_f, Gen.adj_fgp_s_scalar_21_ng_leaf_f, Gen.adj_fgp_s_scalar_21_ng_rg_gp, Gen.adj_fgp_s_scalar_21_ng_leaf_gp, Gen.adj_fgp_s_scalar_21_ng_rg_z_after, Gen.adj_fgp_s_scalar_21_ng_leaf_z_after]

theorem adj_fgp_s_scalar_21_en_unused_param_zero (f0 : K → K → K → K → K) (f0_d1 : K → K → K → K → K) (f0_d2 : K → K → K → K → K) (f0_d3 : K → K → K → K → K) (f1 : K → K → K → K → K) (f1_d1 : K → K → K → K → K) (f1_d2 : K → K → K → K → K) (f1_d3 : K → K → K → K → K) (g00 : K → K → K → K → K) (g00_d1 : K → K → K → K → K) (g00_d11 : K → K → K → K → K) (g00_d12 : K → K → K → K → K) (g00_d13 : K → K → K → K → K) (g00_d2 : K → K → K → K → K) (g00_d22 : K → K → K → K → K) (g00_d23 : K → K → K → K → K) (g00_d3 : K → K → K → K → K) (g10 : K → K → K → K → K) (g10_d1 : K → K → K → K → K) (g10_d11 : K → K → K → K → K) (g10_d12 : K → K → K → K → K) (g10_d13 : K → K → K → K → K) (g10_d2 : K → K → K → K → K) (g10_d22 : K → K → K → K → K) (g10_d23 : K → K → K → K → K) (g10_d3 : K → K → K → K → K) (t y0 y1 a0 a1 b bu th thu v0 : K) :
    Gen.adj_fgp_s_scalar_21_en_f_0_5 f0 f0_d1 f0_d2 f0_d3 f1 f1_d1 f1_d2 f1_d3 g00 g00_d1 g00_d2 g00_d3 g10 g10_d1 g10_d2 g10_d3 t y0 y1 a0 a1 b bu th thu v0 = 0 ∧
    Gen.adj_fgp_s_scalar_21_en_gp_0_5 f0 f0_d1 f0_d2 f0_d3 f1 f1_d1 f1_d2 f1_d3 g00 g00_d1 g00_d2 g00_d3 g10 g10_d1 g10_d2 g10_d3 t y0 y1 a0 a1 b bu th thu v0 = 0 := by
  refine ⟨?_, ?_⟩ <;> simp [Gen.adj_fgp_s_scalar_21_en_f_0_5, Gen.adj_fgp_s_scalar_21_en_gp_0_5]

theorem adj_fgp_s_scalar_21_en_pair (f0 : K → K → K → K → K) (f0_d1 : K → K → K → K → K) (f0_d2 : K → K → K → K → K) (f0_d3 : K → K → K → K → K) (f1 : K → K → K → K → K) (f1_d1 : K → K → K → K → K) (f1_d2 : K → K → K → K → K) (f1_d3 : K → K → K → K → K) (g00 : K → K → K → K → K) (g00_d1 : K → K → K → K → K) (g00_d11 : K → K → K → K → K) (g00_d12 : K → K → K → K → K) (g00_d13 : K → K → K → K → K) (g00_d2 : K → K → K → K → K) (g00_d22 : K → K → K → K → K) (g00_d23 : K → K → K → K → K) (g00_d3 : K → K → K → K → K) (g10 : K → K → K → K → K) (g10_d1 : K → K → K → K → K) (g10_d11 : K → K → K → K → K) (g10_d12 : K → K → K → K → K) (g10_d13 : K → K → K → K → K) (g10_d2 : K → K → K → K → K) (g10_d22 : K → K → K → K → K) (g10_d23 : K → K → K → K → K) (g10_d3 : K → K → K → K → K) (t y0 y1 a0 a1 b bu th thu v0 : K) :
    Gen.adj_fgp_s_scalar_21_en_f_0_0 f0 f0_d1 f0_d2 f0_d3 f1 f1_d1 f1_d2 f1_d3 g00 g00_d1 g00_d2 g00_d3 g10 g10_d1 g10_d2 g10_d3 t y0 y1 a0 a1 b bu th thu v0
      = Gen.adj_f_s_scalar_21_en_out_0_0 f0 f0_d1 f0_d2 f0_d3 f1 f1_d1 f1_d2 f1_d3 t y0 y1 a0 a1 b bu th thu ∧
    Gen.adj_fgp_s_scalar_21_en_f_0_1 f0 f0_d1 f0_d2 f0_d3 f1 f1_d1 f1_d2 f1_d3 g00 g00_d1 g00_d2 g00_d3 g10 g10_d1 g10_d2 g10_d3 t y0 y1 a0 a1 b bu th thu v0
      = Gen.adj_f_s_scalar_21_en_out_0_1 f0 f0_d1 f0_d2 f0_d3 f1 f1_d1 f1_d2 f1_d3 t y0 y1 a0 a1 b bu th thu ∧
    Gen.adj_fgp_s_scalar_21_en_f_0_2 f0 f0_d1 f0_d2 f0_d3 f1 f1_d1 f1_d2 f1_d3 g00 g00_d1 g00_d2 g00_d3 g10 g10_d1 g10_d2 g10_d3 t y0 y1 a0 a1 b bu th thu v0
      = Gen.adj_f_s_scalar_21_en_out_0_2 f0 f0_d1 f0_d2 f0_d3 f1 f1_d1 f1_d2 f1_d3 t y0 y1 a0 a1 b bu th thu ∧
    Gen.adj_fgp_s_scalar_21_en_f_0_3 f0 f0_d1 f0_d2 f0_d3 f1 f1_d1 f1_d2 f1_d3 g00 g00_d1 g00_d2 g00_d3 g10 g10_d1 g10_d2 g10_d3 t y0 y1 a0 a1 b bu th thu v0
      = Gen.adj_f_s_scalar_21_en_out_0_3 f0 f0_d1 f0_d2 f0_d3 f1 f1_d1 f1_d2 f1_d3 t y0 y1 a0 a1 b bu th thu ∧
    Gen.adj_fgp_s_scalar_21_en_f_0_4 f0 f0_d1 f0_d2 f0_d3 f1 f1_d1 f1_d2 f1_d3 g00 g00_d1 g00_d2 g00_d3 g10 g10_d1 g10_d2 g10_d3 t y0 y1 a0 a1 b bu th thu v0
      = Gen.adj_f_s_scalar_21_en_out_0_4 f0 f0_d1 f0_d2 f0_d3 f1 f1_d1 f1_d2 f1_d3 t y0 y1 a0 a1 b bu th thu ∧
    Gen.adj_fgp_s_scalar_21_en_f_0_5 f0 f0_d1 f0_d2 f0_d3 f1 f1_d1 f1_d2 f1_d3 g00 g00_d1 g00_d2 g00_d3 g10 g10_d1 g10_d2 g10_d3 t y0 y1 a0 a1 b bu th thu v0
      = Gen.adj_f_s_scalar_21_en_out_0_5 f0 f0_d1 f0_d2 f0_d3 f1 f1_d1 f1_d2 f1_d3 t y0 y1 a0 a1 b bu th thu ∧
    Gen.adj_fgp_s_scalar_21_en_gp_0_0 f0 f0_d1 f0_d2 f0_d3 f1 f1_d1 f1_d2 f1_d3 g00 g00_d1 g00_d2 g00_d3 g10 g10_d1 g10_d2 g10_d3 t y0 y1 a0 a1 b bu th thu v0
      = Gen.adj_gp_s_scalar_21_en_out_0_0 g00 g00_d1 g00_d2 g00_d3 g10 g10_d1 g10_d2 g10_d3 t y0 y1 a0 a1 b bu th thu v0 ∧
    Gen.adj_fgp_s_scalar_21_en_gp_0_1 f0 f0_d1 f0_d2 f0_d3 f1 f1_d1 f1_d2 f1_d3 g00 g00_d1 g00_d2 g00_d3 g10 g10_d1 g10_d2 g10_d3 t y0 y1 a0 a1 b bu th thu v0
      = Gen.adj_gp_s_scalar_21_en_out_0_1 g00 g00_d1 g00_d2 g00_d3 g10 g10_d1 g10_d2 g10_d3 t y0 y1 a0 a1 b bu th thu v0 ∧
    Gen.adj_fgp_s_scalar_21_en_gp_0_2 f0 f0_d1 f0_d2 f0_d3 f1 f1_d1 f1_d2 f1_d3 g00 g00_d1 g00_d2 g00_d3 g10 g10_d1 g10_d2 g10_d3 t y0 y1 a0 a1 b bu th thu v0
      = Gen.adj_gp_s_scalar_21_en_out_0_2 g00 g00_d1 g00_d2 g00_d3 g10 g10_d1 g10_d2 g10_d3 t y0 y1 a0 a1 b bu th thu v0 ∧
    Gen.adj_fgp_s_scalar_21_en_gp_0_3 f0 f0_d1 f0_d2 f0_d3 f1 f1_d1 f1_d2 f1_d3 g00 g00_d1 g00_d2 g00_d3 g10 g10_d1 g10_d2 g10_d3 t y0 y1 a0 a1 b bu th thu v0
      = Gen.adj_gp_s_scalar_21_en_out_0_3 g00 g00_d1 g00_d2 g00_d3 g10 g10_d1 g10_d2 g10_d3 t y0 y1 a0 a1 b bu th thu v0 ∧
    Gen.adj_fgp_s_scalar_21_en_gp_0_4 f0 f0_d1 f0_d2 f0_d3 f1 f1_d1 f1_d2 f1_d3 g00 g00_d1 g00_d2 g00_d3 g10 g10_d1 g10_d2 g10_d3 t y0 y1 a0 a1 b bu th thu v0
      = Gen.adj_gp_s_scalar_21_en_out_0_4 g00 g00_d1 g00_d2 g00_d3 g10 g10_d1 g10_d2 g10_d3 t y0 y1 a0 a1 b bu th thu v0 ∧
    Gen.adj_fgp_s_scalar_21_en_gp_0_5 f0 f0_d1 f0_d2 f0_d3 f1 f1_d1 f1_d2 f1_d3 g00 g00_d1 g00_d2 g00_d3 g10 g10_d1 g10_d2 g10_d3 t y0 y1 a0 a1 b bu th thu v0
      = Gen.adj_gp_s_scalar_21_en_out_0_5 g00 g00_d1 g00_d2 g00_d3 g10 g10_d1 g10_d2 g10_d3 t y0 y1 a0 a1 b bu th thu v0 := by
  refine ⟨?_, ?_, ?_, ?_, ?_, ?_, ?_, ?_, ?_, ?_, ?_, ?_⟩ <;> simp only [Gen.adj_fgp_s_scalar_21_en_f_0_0, Gen.adj_f_s_scalar_21_en_out_0_0, Gen.adj_fgp_s_scalar_21_en_f_0_1, Gen.adj_f_s_scalar_21_en_out_0_1, Gen.adj_fgp_s_scalar_21_en_f_0_2, Gen.adj_f_s_scalar_21_en_out_0_2, Gen.adj_fgp_s_scalar_21_en_f_0_3, Gen.adj_f_s_scalar_21_en_out_0_3, Gen.adj_fgp_s_scalar_21_en_f_0_4, Gen.adj_f_s_scalar_21_en_out_0_4, Gen.adj_fgp_s_scalar_21_en_f_0_5, Gen.adj_f_s_scalar_21_en_out_0_5, Gen.adj_fgp_s_scalar_21_en_gp_0_0, Gen.adj_gp_s_scalar_21_en_out_0_0, Gen.adj_fgp_s_scalar_21_en_gp_0_1, Gen.adj_gp_s_scalar_21_en_out_0_1, Gen.adj_fgp_s_scalar_21_en_gp_0_2, Gen.adj_gp_s_scalar_21_en_out_0_2, Gen.adj_fgp_s_scalar_21_en_gp_0_3, Gen.adj_gp_s_scalar_21_en_out_0_3, Gen.adj_fgp_s_scalar_21_en_gp_0_4, Gen.adj_gp_s_scalar_21_en_out_0_4, Gen.adj_fgp_s_scalar_21_en_gp_0_5, Gen.adj_gp_s_scalar_21_en_out_0_5] <;> ring

theorem adj_fgp_s_scalar_21_en_graph (f0 : K → K → K → K → K) (f0_d1 : K → K → K → K → K) (f0_d2 : K → K → K → K → K) (f0_d3 : K → K → K → K → K) (f1 : K → K → K → K → K) (f1_d1 : K → K → K → K → K) (f1_d2 : K → K → K → K → K) (f1_d3 : K → K → K → K → K) (g00 : K → K → K → K → K) (g00_d1 : K → K → K → K → K) (g00_d11 : K → K → K → K → K) (g00_d12 : K → K → K → K → K) (g00_d13 : K → K → K → K → K) (g00_d2 : K → K → K → K → K) (g00_d22 : K → K → K → K → K) (g00_d23 : K → K → K → K → K) (g00_d3 : K → K → K → K → K) (g10 : K → K → K → K → K) (g10_d1 : K → K → K → K → K) (g10_d11 : K → K → K → K → K) (g10_d12 : K → K → K → K → K) (g10_d13 : K → K → K → K → K) (g10_d2 : K → K → K → K → K) (g10_d22 : K → K → K → K → K) (g10_d23 : K → K → K → K → K) (g10_d3 : K → K → K → K → K) (t y0 y1 a0 a1 b bu th thu v0 : K) :
    Gen.adj_fgp_s_scalar_21_en_rg_f f0 f0_d1 f0_d2 f0_d3 f1 f1_d1 f1_d2 f1_d3 g00 g00_d1 g00_d2 g00_d3 g10 g10_d1 g10_d2 g10_d3 t y0 y1 a0 a1 b bu th thu v0 = 1 ∧
    Gen.adj_fgp_s_scalar_21_en_leaf_f f0 f0_d1 f0_d2 f0_d3 f1 f1_d1 f1_d2 f1_d3 g00 g00_d1 g00_d2 g00_d3 g10 g10_d1 g10_d2 g10_d3 t y0 y1 a0 a1 b bu th thu v0 = 0 ∧
    Gen.adj_fgp_s_scalar_21_en_rg_gp f0 f0_d1 f0_d2 f0_d3 f1 f1_d1 f1_d2 f1_d3 g00 g00_d1 g00_d2 g00_d3 g10 g10_d1 g10_d2 g10_d3 t y0 y1 a0 a1 b bu th thu v0 = 1 ∧
    Gen.adj_fgp_s_scalar_21_en_leaf_gp f0 f0_d1 f0_d2 f0_d3 f1 f1_d1 f1_d2 f1_d3 g00 g00_d1 g00_d2 g00_d3 g10 g10_d1 g10_d2 g10_d3 t y0 y1 a0 a1 b bu th thu v0 = 0 ∧
    Gen.adj_fgp_s_scalar_21_en_rg_z_after f0 f0_d1 f0_d2 f0_d3 f1 f1_d1 f1_d2 f1_d3 g00 g00_d1 g00_d2 g00_d3 g10 g10_d1 g10_d2 g10_d3 t y0 y1 a0 a1 b bu th thu v0 = 1 ∧
    Gen.adj_fgp_s_scalar_21_en_leaf_z_after f0 f0_d1 f0_d2 f0_d3 f1 f1_d1 f1_d2 f1_d3 g00 g00_d1 g00_d2 g00_d3 g10 g10_d1 g10_d2 g10_d3 t y0 y1 a0 a1 b bu th thu v0 = 1 := by
  refine ⟨?_, ?_, ?_, ?_, ?_, ?_⟩ <;> simp only [Gen.adj_fgp_s_scalar_21_en_rg_f, Gen.adj_fgp_s_scalar_21_en_leaf_f, Gen.adj_fgp_s_scalar_21_en_rg_gp, Gen.adj_fgp_s_scalar_21_en_leaf_gp, Gen.adj_fgp_s_scalar_21_en_rg_z_after, Gen.adj_fgp_s_scalar_21_en_leaf_z_after]

theorem adj_f_s_general_11_ng_spec (f : K → K → K → K) (f_d1 : K → K → K → K) (f_d2 : K → K → K → K) (g : K → K → K → K) (g_d1 : K → K → K → K) (g_d11 : K → K → K → K) (g_d12 : K → K → K → K) (g_d2 : K → K → K → K) (t y0 a0 b bu th thu : K) :
    Gen.adj_f_s_general_11_ng_out_0_0 f f_d1 f_d2 t y0 a0 b bu th thu
      = stratDriftY (jet_general_11 f f_d1 f_d2 g g_d1 g_d11 g_d12 g_d2 t y0 th) 0 ∧
    Gen.adj_f_s_general_11_ng_out_0_1 f f_d1 f_d2 t y0 a0 b bu th thu
      = stratDriftA (jet_general_11 f f_d1 f_d2 g g_d1 g_d11 g_d12 g_d2 t y0 th) ![a0] 0 ∧
    Gen.adj_f_s_general_11_ng_out_0_2 f f_d1 f_d2 t y0 a0 b bu th thu
      = stratDriftTh (jet_general_11 f f_d1 f_d2 g g_d1 g_d11 g_d12 g_d2 t y0 th) ![a0] 0 ∧
    Gen.adj_f_s_general_11_ng_out_0_3 f f_d1 f_d2 t y0 a0 b bu th thu
      = stratDriftTh (jet_general_11 f f_d1 f_d2 g g_d1 g_d11 g_d12 g_d2 t y0 th) ![a0] 1 := by
  refine ⟨?_, ?_, ?_, ?_⟩ <;>
  simp [Gen.adj_f_s_general_11_ng_out_0_0, Gen.adj_f_s_general_11_ng_out_0_1, Gen.adj_f_s_general_11_ng_out_0_2, Gen.adj_f_s_general_11_ng_out_0_3, jet_general_11, stratDriftY, stratDriftA, stratDriftTh, itoDriftY, itoDriftA, itoDriftTh, gProdY, gProdA, gProdTh, gdgY, gdgA, gdgTh, driftY, driftA, driftTh, diffY, diffA, diffTh, itoCorr, itoCorrY, itoCorrTh, fStrat, fStratY, fStratTh, colCorrY, colCorrA, colCorrTh, Fin.sum_univ_two, Fin.sum_univ_one, Fin.isValue, Matrix.cons_val_zero, Matrix.cons_val_one, Matrix.cons_val_fin_one, Matrix.head_cons] <;> ring

theorem adj_f_s_general_11_ng_unused_param_zero (f : K → K → K → K) (f_d1 : K → K → K → K) (f_d2 : K → K → K → K) (g : K → K → K → K) (g_d1 : K → K → K → K) (g_d11 : K → K → K → K) (g_d12 : K → K → K → K) (g_d2 : K → K → K → K) (t y0 a0 b bu th thu : K) :
    Gen.adj_f_s_general_11_ng_out_0_3 f f_d1 f_d2 t y0 a0 b bu th thu = 0 := by
  simp [Gen.adj_f_s_general_11_ng_out_0_3]

theorem adj_f_s_general_11_ng_graph (f : K → K → K → K) (f_d1 : K → K → K → K) (f_d2 : K → K → K → K) (g : K → K → K → K) (g_d1 : K → K → K → K) (g_d11 : K → K → K → K) (g_d12 : K → K → K → K) (g_d2 : K → K → K → K) (t y0 a0 b bu th thu : K) :
    Gen.adj_f_s_general_11_ng_rg_out f f_d1 f_d2 t y0 a0 b bu th thu = 0 ∧
    Gen.adj_f_s_general_11_ng_leaf_out f f_d1 f_d2 t y0 a0 b bu th thu = 1 ∧
    Gen.adj_f_s_general_11_ng_rg_z_after f f_d1 f_d2 t y0 a0 b bu th thu = 0 ∧
    Gen.adj_f_s_general_11_ng_leaf_z_after f f_d1 f_d2 t y0 a0 b bu th thu = 1 := by
  refine ⟨?_, ?_, ?_, ?_⟩ <;> simp only [Gen.adj_f_s_general_11_ng_rg_out, Gen.adj_f_s_general_11_ng_leaf_out, Gen.adj_f_s_general_11_ng_rg_z_after, Gen.adj_f_s_general_11_ng_leaf_z_after]

theorem adj_f_s_general_11_en_spec (f : K → K → K → K) (f_d1 : K → K → K → K) (f_d11 : K → K → K → K) (f_d12 : K → K → K → K) (f_d2 : K → K → K → K) (f_d22 : K → K → K → K) (g : K → K → K → K) (g_d1 : K → K → K → K) (g_d11 : K → K → K → K) (g_d12 : K → K → K → K) (g_d2 : K → K → K → K) (t y0 a0 b bu th thu : K) :
    Gen.adj_f_s_general_11_en_out_0_0 f f_d1 f_d11 f_d12 f_d2 f_d22 t y0 a0 b bu th thu
      = stratDriftY (jet_general_11 f f_d1 f_d2 g g_d1 g_d11 g_d12 g_d2 t y0 th) 0 ∧
    Gen.adj_f_s_general_11_en_out_0_1 f f_d1 f_d11 f_d12 f_d2 f_d22 t y0 a0 b bu th thu
      = stratDriftA (jet_general_11 f f_d1 f_d2 g g_d1 g_d11 g_d12 g_d2 t y0 th) ![a0] 0 ∧
    Gen.adj_f_s_general_11_en_out_0_2 f f_d1 f_d11 f_d12 f_d2 f_d22 t y0 a0 b bu th thu
      = stratDriftTh (jet_general_11 f f_d1 f_d2 g g_d1 g_d11 g_d12 g_d2 t y0 th) ![a0] 0 ∧
    Gen.adj_f_s_general_11_en_out_0_3 f f_d1 f_d11 f_d12 f_d2 f_d22 t y0 a0 b bu th thu
      = stratDriftTh (jet_general_11 f f_d1 f_d2 g g_d1 g_d11 g_d12 g_d2 t y0 th) ![a0] 1 := by
  refine ⟨?_, ?_, ?_, ?_⟩ <;>
  simp [Gen.adj_f_s_general_11_en_out_0_0, Gen.adj_f_s_general_11_en_out_0_1, Gen.adj_f_s_general_11_en_out_0_2, Gen.adj_f_s_general_11_en_out_0_3, jet_general_11, stratDriftY, stratDriftA, stratDriftTh, itoDriftY, itoDriftA, itoDriftTh, gProdY, gProdA, gProdTh, gdgY, gdgA, gdgTh, driftY, driftA, driftTh, diffY, diffA, diffTh, itoCorr, itoCorrY, itoCorrTh, fStrat, fStratY, fStratTh, colCorrY, colCorrA, colCorrTh, Fin.sum_univ_two, Fin.sum_univ_one, Fin.isValue, Matrix.cons_val_zero, Matrix.cons_val_one, Matrix.cons_val_fin_one, Matrix.head_cons] <;> ring

theorem adj_f_s_general_11_en_unused_param_zero (f : K → K → K → K) (f_d1 : K → K → K → K) (f_d11 : K → K → K → K) (f_d12 : K → K → K → K) (f_d2 : K → K → K → K) (f_d22 : K → K → K → K) (g : K → K → K → K) (g_d1 : K → K → K → K) (g_d11 : K → K → K → K) (g_d12 : K → K → K → K) (g_d2 : K → K → K → K) (t y0 a0 b bu th thu : K) :
    Gen.adj_f_s_general_11_en_out_0_3 f f_d1 f_d11 f_d12 f_d2 f_d22 t y0 a0 b bu th thu = 0 := by
  simp [Gen.adj_f_s_general_11_en_out_0_3]

theorem adj_f_s_general_11_en_graph (f : K → K → K → K) (f_d1 : K → K → K → K) (f_d11 : K → K → K → K) (f_d12 : K → K → K → K) (f_d2 : K → K → K → K) (f_d22 : K → K → K → K) (g : K → K → K → K) (g_d1 : K → K → K → K) (g_d11 : K → K → K → K) (g_d12 : K → K → K → K) (g_d2 : K → K → K → K) (t y0 a0 b bu th thu : K) :
    Gen.adj_f_s_general_11_en_rg_out f f_d1 f_d11 f_d12 f_d2 f_d22 t y0 a0 b bu th thu = 1 ∧
    Gen.adj_f_s_general_11_en_leaf_out f f_d1 f_d11 f_d12 f_d2 f_d22 t y0 a0 b bu th thu = 0 ∧
    Gen.adj_f_s_general_11_en_rg_z_after f f_d1 f_d11 f_d12 f_d2 f_d22 t y0 a0 b bu th thu = 1 ∧
    Gen.adj_f_s_general_11_en_leaf_z_after f f_d1 f_d11 f_d12 f_d2 f_d22 t y0 a0 b bu th thu = 1 := by
  refine ⟨?_, ?_, ?_, ?_⟩ <;> simp only [Gen.adj_f_s_general_11_en_rg_out, Gen.adj_f_s_general_11_en_leaf_out, Gen.adj_f_s_general_11_en_rg_z_after, Gen.adj_f_s_general_11_en_leaf_z_after]

theorem adj_gp_s_general_11_ng_spec (f : K → K → K → K) (f_d1 : K → K → K → K) (f_d2 : K → K → K → K) (g : K → K → K → K) (g_d1 : K → K → K → K) (g_d11 : K → K → K → K) (g_d12 : K → K → K → K) (g_d2 : K → K → K → K) (t y0 a0 b bu th thu v0 : K) :
    Gen.adj_gp_s_general_11_ng_out_0_0 g g_d1 g_d2 t y0 a0 b bu th thu v0
      = gProdY (jet_general_11 f f_d1 f_d2 g g_d1 g_d11 g_d12 g_d2 t y0 th) ![v0] 0 ∧
    Gen.adj_gp_s_general_11_ng_out_0_1 g g_d1 g_d2 t y0 a0 b bu th thu v0
      = gProdA (jet_general_11 f f_d1 f_d2 g g_d1 g_d11 g_d12 g_d2 t y0 th) ![a0] ![v0] 0 ∧
    Gen.adj_gp_s_general_11_ng_out_0_2 g g_d1 g_d2 t y0 a0 b bu th thu v0
      = gProdTh (jet_general_11 f f_d1 f_d2 g g_d1 g_d11 g_d12 g_d2 t y0 th) ![a0] ![v0] 0 ∧
    Gen.adj_gp_s_general_11_ng_out_0_3 g g_d1 g_d2 t y0 a0 b bu th thu v0
      = gProdTh (jet_general_11 f f_d1 f_d2 g g_d1 g_d11 g_d12 g_d2 t y0 th) ![a0] ![v0] 1 := by
  refine ⟨?_, ?_, ?_, ?_⟩ <;>
  simp [Gen.adj_gp_s_general_11_ng_out_0_0, Gen.adj_gp_s_general_11_ng_out_0_1, Gen.adj_gp_s_general_11_ng_out_0_2, Gen.adj_gp_s_general_11_ng_out_0_3, jet_general_11, stratDriftY, stratDriftA, stratDriftTh, itoDriftY, itoDriftA, itoDriftTh, gProdY, gProdA, gProdTh, gdgY, gdgA, gdgTh, driftY, driftA, driftTh, diffY, diffA, diffTh, itoCorr, itoCorrY, itoCorrTh, fStrat, fStratY, fStratTh, colCorrY, colCorrA, colCorrTh, Fin.sum_univ_two, Fin.sum_univ_one, Fin.isValue, Matrix.cons_val_zero, Matrix.cons_val_one, Matrix.cons_val_fin_one, Matrix.head_cons] <;> ring

theorem adj_gp_s_general_11_ng_unused_param_zero (f : K → K → K → K) (f_d1 : K → K → K → K) (f_d2 : K → K → K → K) (g : K → K → K → K) (g_d1 : K → K → K → K) (g_d11 : K → K → K → K) (g_d12 : K → K → K → K) (g_d2 : K → K → K → K) (t y0 a0 b bu th thu v0 : K) :
    Gen.adj_gp_s_general_11_ng_out_0_3 g g_d1 g_d2 t y0 a0 b bu th thu v0 = 0 := by
  simp [Gen.adj_gp_s_general_11_ng_out_0_3]

theorem adj_gp_s_general_11_ng_graph (f : K → K → K → K) (f_d1 : K → K → K → K) (f_d2 : K → K → K → K) (g : K → K → K → K) (g_d1 : K → K → K → K) (g_d11 : K → K → K → K) (g_d12 : K → K → K → K) (g_d2 : K → K → K → K) (t y0 a0 b bu th thu v0 : K) :
    Gen.adj_gp_s_general_11_ng_rg_out g g_d1 g_d2 t y0 a0 b bu th thu v0 = 0 ∧
    Gen.adj_gp_s_general_11_ng_leaf_out g g_d1 g_d2 t y0 a0 b bu th thu v0 = 1 ∧
    Gen.adj_gp_s_general_11_ng_rg_z_after g g_d1 g_d2 t y0 a0 b bu th thu v0 = 0 ∧
    Gen.adj_gp_s_general_11_ng_leaf_z_after g g_d1 g_d2 t y0 a0 b bu th thu v0 = 1 := by
  refine ⟨?_, ?_, ?_, ?_⟩ <;> simp only [Gen.adj_gp_s_general_11_ng_rg_out, Gen.adj_gp_s_general_11_ng_leaf_out, Gen.adj_gp_s_general_11_ng_rg_z_after, Gen.adj_gp_s_general_11_ng_leaf_z_after]

theorem adj_gp_s_general_11_en_spec (f : K → K → K → K) (f_d1 : K → K → K → K) (f_d2 : K → K → K → K) (g : K → K → K → K) (g_d1 : K → K → K → K) (g_d11 : K → K → K → K) (g_d12 : K → K → K → K) (g_d2 : K → K → K → K) (g_d22 : K → K → K → K) (t y0 a0 b bu th thu v0 : K) :
    Gen.adj_gp_s_general_11_en_out_0_0 g g_d1 g_d11 g_d12 g_d2 g_d22 t y0 a0 b bu th thu v0
      = gProdY (jet_general_11 f f_d1 f_d2 g g_d1 g_d11 g_d12 g_d2 t y0 th) ![v0] 0 ∧
    Gen.adj_gp_s_general_11_en_out_0_1 g g_d1 g_d11 g_d12 g_d2 g_d22 t y0 a0 b bu th thu v0
      = gProdA (jet_general_11 f f_d1 f_d2 g g_d1 g_d11 g_d12 g_d2 t y0 th) ![a0] ![v0] 0 ∧
    Gen.adj_gp_s_general_11_en_out_0_2 g g_d1 g_d11 g_d12 g_d2 g_d22 t y0 a0 b bu th thu v0
      = gProdTh (jet_general_11 f f_d1 f_d2 g g_d1 g_d11 g_d12 g_d2 t y0 th) ![a0] ![v0] 0 ∧
    Gen.adj_gp_s_general_11_en_out_0_3 g g_d1 g_d11 g_d12 g_d2 g_d22 t y0 a0 b bu th thu v0
      = gProdTh (jet_general_11 f f_d1 f_d2 g g_d1 g_d11 g_d12 g_d2 t y0 th) ![a0] ![v0] 1 := by
  refine ⟨?_, ?_, ?_, ?_⟩ <;>
  simp [Gen.adj_gp_s_general_11_en_out_0_0, Gen.adj_gp_s_general_11_en_out_0_1, Gen.adj_gp_s_general_11_en_out_0_2, Gen.adj_gp_s_general_11_en_out_0_3, jet_general_11, stratDriftY, stratDriftA, stratDriftTh, itoDriftY, itoDriftA, itoDriftTh, gProdY, gProdA, gProdTh, gdgY, gdgA, gdgTh, driftY, driftA, driftTh, diffY, diffA, diffTh, itoCorr, itoCorrY, itoCorrTh, fStrat, fStratY, fStratTh, colCorrY, colCorrA, colCorrTh, Fin.sum_univ_two, Fin.sum_univ_one, Fin.isValue, Matrix.cons_val_zero, Matrix.cons_val_one, Matrix.cons_val_fin_one, Matrix.head_cons] <;> ring

theorem adj_gp_s_general_11_en_unused_param_zero (f : K → K → K → K) (f_d1 : K → K → K → K) (f_d2 : K → K → K → K) (g : K → K → K → K) (g_d1 : K → K → K → K) (g_d11 : K → K → K → K) (g_d12 : K → K → K → K) (g_d2 : K → K → K → K) (g_d22 : K → K → K → K) (t y0 a0 b bu th thu v0 : K) :
    Gen.adj_gp_s_general_11_en_out_0_3 g g_d1 g_d11 g_d12 g_d2 g_d22 t y0 a0 b bu th thu v0 = 0 := by
  simp [Gen.adj_gp_s_general_11_en_out_0_3]

theorem adj_gp_s_general_11_en_graph (f : K → K → K → K) (f_d1 : K → K → K → K) (f_d2 : K → K → K → K) (g : K → K → K → K) (g_d1 : K → K → K → K) (g_d11 : K → K → K → K) (g_d12 : K → K → K → K) (g_d2 : K → K → K → K) (g_d22 : K → K → K → K) (t y0 a0 b bu th thu v0 : K) :
    Gen.adj_gp_s_general_11_en_rg_out g g_d1 g_d11 g_d12 g_d2 g_d22 t y0 a0 b bu th thu v0 = 1 ∧
    Gen.adj_gp_s_general_11_en_leaf_out g g_d1 g_d11 g_d12 g_d2 g_d22 t y0 a0 b bu th thu v0 = 0 ∧
    Gen.adj_gp_s_general_11_en_rg_z_after g g_d1 g_d11 g_d12 g_d2 g_d22 t y0 a0 b bu th thu v0 = 1 ∧
    Gen.adj_gp_s_general_11_en_leaf_z_after g g_d1 g_d11 g_d12 g_d2 g_d22 t y0 a0 b bu th thu v0 = 1 := by
  refine ⟨?_, ?_, ?_, ?_⟩ <;> simp only [Gen.adj_gp_s_general_11_en_rg_out, Gen.adj_gp_s_general_11_en_leaf_out, Gen.adj_gp_s_general_11_en_rg_z_after, Gen.adj_gp_s_general_11_en_leaf_z_after]

theorem adj_fgp_s_general_11_ng_unused_param_zero (f : K → K → K → K) (f_d1 : K → K → K → K) (f_d2 : K → K → K → K) (g : K → K → K → K) (g_d1 : K → K → K → K) (g_d11 : K → K → K → K) (g_d12 : K → K → K → K) (g_d2 : K → K → K → K) (t y0 a0 b bu th thu v0 : K) :
    Gen.adj_fgp_s_general_11_ng_f_0_3 f f_d1 f_d2 g g_d1 g_d2 t y0 a0 b bu th thu v0 = 0 ∧
    Gen.adj_fgp_s_general_11_ng_gp_0_3 f f_d1 f_d2 g g_d1 g_d2 t y0 a0 b bu th thu v0 = 0 := by
  refine ⟨?_, ?_⟩ <;> simp [Gen.adj_fgp_s_general_11_ng_f_0_3, Gen.adj_fgp_s_general_11_ng_gp_0_3]

theorem adj_fgp_s_general_11_ng_pair (f : K → K → K → K) (f_d1 : K → K → K → K) (f_d2 : K → K → K → K) (g : K → K → K → K) (g_d1 : K → K → K → K) (g_d11 : K → K → K → K) (g_d12 : K → K → K → K) (g_d2 : K → K → K → K) (t y0 a0 b bu th thu v0 : K) :
    Gen.adj_fgp_s_general_11_ng_f_0_0 f f_d1 f_d2 g g_d1 g_d2 t y0 a0 b bu th thu v0
      = Gen.adj_f_s_general_11_ng_out_0_0 f f_d1 f_d2 t y0 a0 b bu th thu ∧
    Gen.adj_fgp_s_general_11_ng_f_0_1 f f_d1 f_d2 g g_d1 g_d2 t y0 a0 b bu th thu v0
      = Gen.adj_f_s_general_11_ng_out_0_1 f f_d1 f_d2 t y0 a0 b bu th thu ∧
    Gen.adj_fgp_s_general_11_ng_f_0_2 f f_d1 f_d2 g g_d1 g_d2 t y0 a0 b bu th thu v0
      = Gen.adj_f_s_general_11_ng_out_0_2 f f_d1 f_d2 t y0 a0 b bu th thu ∧
    Gen.adj_fgp_s_general_11_ng_f_0_3 f f_d1 f_d2 g g_d1 g_d2 t y0 a0 b bu th thu v0
      = Gen.adj_f_s_general_11_ng_out_0_3 f f_d1 f_d2 t y0 a0 b bu th thu ∧
    Gen.adj_fgp_s_general_11_ng_gp_0_0 f f_d1 f_d2 g g_d1 g_d2 t y0 a0 b bu th thu v0
      = Gen.adj_gp_s_general_11_ng_out_0_0 g g_d1 g_d2 t y0 a0 b bu th thu v0 ∧
    Gen.adj_fgp_s_general_11_ng_gp_0_1 f f_d1 f_d2 g g_d1 g_d2 t y0 a0 b bu th thu v0
      = Gen.adj_gp_s_general_11_ng_out_0_1 g g_d1 g_d2 t y0 a0 b bu th thu v0 ∧
    Gen.adj_fgp_s_general_11_ng_gp_0_2 f f_d1 f_d2 g g_d1 g_d2 t y0 a0 b bu th thu v0
      = Gen.adj_gp_s_general_11_ng_out_0_2 g g_d1 g_d2 t y0 a0 b bu th thu v0 ∧
    Gen.adj_fgp_s_general_11_ng_gp_0_3 f f_d1 f_d2 g g_d1 g_d2 t y0 a0 b bu th thu v0
      = Gen.adj_gp_s_general_11_ng_out_0_3 g g_d1 g_d2 t y0 a0 b bu th thu v0 := by
  refine ⟨?_, ?_, ?_, ?_, ?_, ?_, ?_, ?_⟩ <;> simp only [Gen.adj_fgp_s_general_11_ng_f_0_0, Gen.adj_f_s_general_11_ng_out_0_0, Gen.adj_fgp_s_general_11_ng_f_0_1, Gen.adj_f_s_general_11_ng_out_0_1, Gen.adj_fgp_s_general_11_ng_f_0_2, Gen.adj_f_s_general_11_ng_out_0_2, Gen.adj_fgp_s_general_11_ng_f_0_3, Gen.adj_f_s_general_11_ng_out_0_3, Gen.adj_fgp_s_general_11_ng_gp_0_0, Gen.adj_gp_s_general_11_ng_out_0_0, Gen.adj_fgp_s_general_11_ng_gp_0_1, Gen.adj_gp_s_general_11_ng_out_0_1, Gen.adj_fgp_s_general_11_ng_gp_0_2, Gen.adj_gp_s_general_11_ng_out_0_2, Gen.adj_fgp_s_general_11_ng_gp_0_3, Gen.adj_gp_s_general_11_ng_out_0_3] <;> ring

theorem adj_fgp_s_general_11_ng_graph (f : K → K → K → K) (f_d1 : K → K → K → K) (f_d2 : K → K → K → K) (g : K → K → K → K) (g_d1 : K → K → K → K) (g_d11 : K → K → K → K) (g_d12 : K → K → K → K) (g_d2 : K → K → K → K) (t y0 a0 b bu th thu v0 : K) :
    Gen.adj_fgp_s_general_11_ng_rg_f f f_d1 f_d2 g g_d1 g_d2 t y0 a0 b bu th thu v0 = 0 ∧
    Gen.adj_fgp_s_general_11_ng_leaf_f f f_d1 f_d2 g g_d1 g_d2 t y0 a0 b bu th thu v0 = 1 ∧
    Gen.adj_fgp_s_general_11_ng_rg_gp f f_d1 f_d2 g g_d1 g_d2 t y0 a0 b bu th thu v0 = 0 ∧
    Gen.adj_fgp_s_general_11_ng_leaf_gp f f_d1 f_d2 g g_d1 g_d2 t y0 a0 b bu th thu v0 = 1 ∧
    Gen.adj_fgp_s_general_11_ng_rg_z_after f f_d1 f_d2 g g_d1 g_d2 t y0 a0 b bu th thu v0 = 0 ∧
    Gen.adj_fgp_s_general_11_ng_leaf_z_after f f_d1 f_d2 g g_d1 g_d2 t y0 a0 b bu th thu v0 = 1 := by
  refine ⟨?_, ?_, ?_, ?_, ?_, ?_⟩ <;> simp only [Gen.adj_fgp_s_general_11_ng_rg_f, Gen.adj_fgp_s_general_11_ng_leaf_f, Gen.adj_fgp_s_general_11_ng_rg_gp, Gen.adj_fgp_s_general_11_ng_leaf_gp, Gen.adj_fgp_s_general_11_ng_rg_z_after, Gen.adj_fgp_s_general_11_ng_leaf_z_after]

theorem adj_fgp_s_general_11_en_unused_param_zero (f : K → K → K → K) (f_d1 : K → K → K → K) (f_d2 : K → K → K → K) (g : K → K → K → K) (g_d1 : K → K → K → K) (g_d11 : K → K → K → K) (g_d12 : K → K → K → K) (g_d2 : K → K → K → K) (t y0 a0 b bu th thu v0 : K) :
    Gen.adj_fgp_s_general_11_en_f_0_3 f f_d1 f_d2 g g_d1 g_d2 t y0 a0 b bu th thu v0 = 0 ∧
    Gen.adj_fgp_s_general_11_en_gp_0_3 f f_d1 f_d2 g g_d1 g_d2 t y0 a0 b bu th thu v0 = 0 := by
  refine ⟨?_, ?_⟩ <;> simp [Gen.adj_fgp_s_general_11_en_f_0_3, Gen.adj_fgp_s_general_11_en_gp_0_3]

theorem adj_fgp_s_general_11_en_pair (f : K → K → K → K) (f_d1 : K → K → K → K) (f_d2 : K → K → K → K) (g : K → K → K → K) (g_d1 : K → K → K → K) (g_d11 : K → K → K → K) (g_d12 : K → K → K → K) (g_d2 : K → K → K → K) (t y0 a0 b bu th thu v0 : K) :
    Gen.adj_fgp_s_general_11_en_f_0_0 f f_d1 f_d2 g g_d1 g_d2 t y0 a0 b bu th thu v0
      = Gen.adj_f_s_general_11_en_out_0_0 f f_d1 f_d11 f_d12 f_d2 f_d22 t y0 a0 b bu th thu ∧
    Gen.adj_fgp_s_general_11_en_f_0_1 f f_d1 f_d2 g g_d1 g_d2 t y0 a0 b bu th thu v0
      = Gen.adj_f_s_general_11_en_out_0_1 f f_d1 f_d11 f_d12 f_d2 f_d22 t y0 a0 b bu th thu ∧
    Gen.adj_fgp_s_general_11_en_f_0_2 f f_d1 f_d2 g g_d1 g_d2 t y0 a0 b bu th thu v0
      = Gen.adj_f_s_general_11_en_out_0_2 f f_d1 f_d11 f_d12 f_d2 f_d22 t y0 a0 b bu th thu ∧
    Gen.adj_fgp_s_general_11_en_f_0_3 f f_d1 f_d2 g g_d1 g_d2 t y0 a0 b bu th thu v0
      = Gen.adj_f_s_general_11_en_out_0_3 f f_d1 f_d11 f_d12 f_d2 f_d22 t y0 a0 b bu th thu ∧
    Gen.adj_fgp_s_general_11_en_gp_0_0 f f_d1 f_d2 g g_d1 g_d2 t y0 a0 b bu th thu v0
      = Gen.adj_gp_s_general_11_en_out_0_0 g g_d1 g_d11 g_d12 g_d2 g_d22 t y0 a0 b bu th thu v0 ∧
    Gen.adj_fgp_s_general_11_en_gp_0_1 f f_d1 f_d2 g g_d1 g_d2 t y0 a0 b bu th thu v0
      = Gen.adj_gp_s_general_11_en_out_0_1 g g_d1 g_d11 g_d12 g_d2 g_d22 t y0 a0 b bu th thu v0 ∧
    Gen.adj_fgp_s_general_11_en_gp_0_2 f f_d1 f_d2 g g_d1 g_d2 t y0 a0 b bu th thu v0
      = Gen.adj_gp_s_general_11_en_out_0_2 g g_d1 g_d11 g_d12 g_d2 g_d22 t y0 a0 b bu th thu v0 ∧
    Gen.adj_fgp_s_general_11_en_gp_0_3 f f_d1 f_d2 g g_d1 g_d2 t y0 a0 b bu th thu v0
      = Gen.adj_gp_s_general_11_en_out_0_3 g g_d1 g_d11 g_d12 g_d2 g_d22 t y0 a0 b bu th thu v0 := by
  refine ⟨?_, ?_, ?_, ?_, ?_, ?_, ?_, ?_⟩ <;> simp only [Gen.adj_fgp_s_general_11_en_f_0_0, Gen.adj_f_s_general_11_en_out_0_0, Gen.adj_fgp_s_general_11_en_f_0_1, Gen.adj_f_s_general_11_en_out_0_1, Gen.adj_fgp_s_general_11_en_f_0_2, Gen.adj_f_s_general_11_en_out_0_2, Gen.adj_fgp_s_general_11_en_f_0_3, Gen.adj_f_s_general_11_en_out_0_3, Gen.adj_fgp_s_general_11_en_gp_0_0, Gen.adj_gp_s_general_11_en_out_0_0, Gen.adj_fgp_s_general_11_en_gp_0_1, Gen.adj_gp_s_general_11_en_out_0_1, Gen.adj_fgp_s_general_11_en_gp_0_2, Gen.adj_gp_s_general_11_en_out_0_2, Gen.adj_fgp_s_general_11_en_gp_0_3, Gen.adj_gp_s_general_11_en_out_0_3] <;> ring

theorem adj_fgp_s_general_11_en_graph (f : K → K → K → K) (f_d1 : K → K → K → K) (f_d2 : K → K → K → K) (g : K → K → K → K) (g_d1 : K → K → K → K) (g_d11 : K → K → K → K) (g_d12 : K → K → K → K) (g_d2 : K → K → K → K) (t y0 a0 b bu th thu v0 : K) :
    Gen.adj_fgp_s_general_11_en_rg_f f f_d1 f_d2 g g_d1 g_d2 t y0 a0 b bu th thu v0 = 1 ∧
    Gen.adj_fgp_s_general_11_en_leaf_f f f_d1 f_d2 g g_d1 g_d2 t y0 a0 b bu th thu v0 = 0 ∧
    Gen.adj_fgp_s_general_11_en_rg_gp f f_d1 f_d2 g g_d1 g_d2 t y0 a0 b bu th thu v0 = 1 ∧
    Gen.adj_fgp_s_general_11_en_leaf_gp f f_d1 f_d2 g g_d1 g_d2 t y0 a0 b bu th thu v0 = 0 ∧
    Gen.adj_fgp_s_general_11_en_rg_z_after f f_d1 f_d2 g g_d1 g_d2 t y0 a0 b bu th thu v0 = 1 ∧
    Gen.adj_fgp_s_general_11_en_leaf_z_after f f_d1 f_d2 g g_d1 g_d2 t y0 a0 b bu th thu v0 = 1 := by
  refine ⟨?_, ?_, ?_, ?_, ?_, ?_⟩ <;> simp only [Gen.adj_fgp_s_general_11_en_rg_f, Gen.adj_fgp_s_general_11_en_leaf_f, Gen.adj_fgp_s_general_11_en_rg_gp, Gen.adj_fgp_s_general_11_en_leaf_gp, Gen.adj_fgp_s_general_11_en_rg_z_after, Gen.adj_fgp_s_general_11_en_leaf_z_after]

theorem adj_f_s_general_22_ng_spec (f0 : K → K → K → K → K) (f0_d1 : K → K → K → K → K) (f0_d2 : K → K → K → K → K) (f0_d3 : K → K → K → K → K) (f1 : K → K → K → K → K) (f1_d1 : K → K → K → K → K) (f1_d2 : K → K → K → K → K) (f1_d3 : K → K → K → K → K) (g00 : K → K → K → K → K) (g00_d1 : K → K → K → K → K) (g00_d11 : K → K → K → K → K) (g00_d12 : K → K → K → K → K) (g00_d13 : K → K → K → K → K) (g00_d2 : K → K → K → K → K) (g00_d22 : K → K → K → K → K) (g00_d23 : K → K → K → K → K) (g00_d3 : K → K → K → K → K) (g01 : K → K → K → K → K) (g01_d1 : K → K → K → K → K) (g01_d11 : K → K → K → K → K) (g01_d12 : K → K → K → K → K) (g01_d13 : K → K → K → K → K) (g01_d2 : K → K → K → K → K) (g01_d22 : K → K → K → K → K) (g01_d23 : K → K → K → K → K) (g01_d3 : K → K → K → K → K) (g10 : K → K → K → K → K) (g10_d1 : K → K → K → K → K) (g10_d11 : K → K → K → K → K) (g10_d12 : K → K → K → K → K) (g10_d13 : K → K → K → K → K) (g10_d2 : K → K → K → K → K) (g10_d22 : K → K → K → K → K) (g10_d23 : K → K → K → K → K) (g10_d3 : K → K → K → K → K) (g11 : K → K → K → K → K) (g11_d1 : K → K → K → K → K) (g11_d11 : K → K → K → K → K) (g11_d12 : K → K → K → K → K) (g11_d13 : K → K → K → K → K) (g11_d2 : K → K → K → K → K) (g11_d22 : K → K → K → K → K) (g11_d23 : K → K → K → K → K) (g11_d3 : K → K → K → K → K) (t y0 y1 a0 a1 b bu th thu : K) :
    Gen.adj_f_s_general_22_ng_out_0_0 f0 f0_d1 f0_d2 f0_d3 f1 f1_d1 f1_d2 f1_d3 t y0 y1 a0 a1 b bu th thu
      = stratDriftY (jet_general_22 f0 f0_d1 f0_d2 f0_d3 f1 f1_d1 f1_d2 f1_d3 g00 g00_d1 g00_d11 g00_d12 g00_d13 g00_d2 g00_d22 g00_d23 g00_d3 g01 g01_d1 g01_d11 g01_d12 g01_d13 g01_d2 g01_d22 g01_d23 g01_d3 g10 g10_d1 g10_d11 g10_d12 g10_d13 g10_d2 g10_d22 g10_d23 g10_d3 g11 g11_d1 g11_d11 g11_d12 g11_d13 g11_d2 g11_d22 g11_d23 g11_d3 t y0 y1 th) 0 ∧
    Gen.adj_f_s_general_22_ng_out_0_1 f0 f0_d1 f0_d2 f0_d3 f1 f1_d1 f1_d2 f1_d3 t y0 y1 a0 a1 b bu th thu
      = stratDriftY (jet_general_22 f0 f0_d1 f0_d2 f0_d3 f1 f1_d1 f1_d2 f1_d3 g00 g00_d1 g00_d11 g00_d12 g00_d13 g00_d2 g00_d22 g00_d23 g00_d3 g01 g01_d1 g01_d11 g01_d12 g01_d13 g01_d2 g01_d22 g01_d23 g01_d3 g10 g10_d1 g10_d11 g10_d12 g10_d13 g10_d2 g10_d22 g10_d23 g10_d3 g11 g11_d1 g11_d11 g11_d12 g11_d13 g11_d2 g11_d22 g11_d23 g11_d3 t y0 y1 th) 1 ∧
    Gen.adj_f_s_general_22_ng_out_0_2 f0 f0_d1 f0_d2 f0_d3 f1 f1_d1 f1_d2 f1_d3 t y0 y1 a0 a1 b bu th thu
      = stratDriftA (jet_general_22 f0 f0_d1 f0_d2 f0_d3 f1 f1_d1 f1_d2 f1_d3 g00 g00_d1 g00_d11 g00_d12 g00_d13 g00_d2 g00_d22 g00_d23 g00_d3 g01 g01_d1 g01_d11 g01_d12 g01_d13 g01_d2 g01_d22 g01_d23 g01_d3 g10 g10_d1 g10_d11 g10_d12 g10_d13 g10_d2 g10_d22 g10_d23 g10_d3 g11 g11_d1 g11_d11 g11_d12 g11_d13 g11_d2 g11_d22 g11_d23 g11_d3 t y0 y1 th) ![a0, a1] 0 ∧
    Gen.adj_f_s_general_22_ng_out_0_3 f0 f0_d1 f0_d2 f0_d3 f1 f1_d1 f1_d2 f1_d3 t y0 y1 a0 a1 b bu th thu
      = stratDriftA (jet_general_22 f0 f0_d1 f0_d2 f0_d3 f1 f1_d1 f1_d2 f1_d3 g00 g00_d1 g00_d11 g00_d12 g00_d13 g00_d2 g00_d22 g00_d23 g00_d3 g01 g01_d1 g01_d11 g01_d12 g01_d13 g01_d2 g01_d22 g01_d23 g01_d3 g10 g10_d1 g10_d11 g10_d12 g10_d13 g10_d2 g10_d22 g10_d23 g10_d3 g11 g11_d1 g11_d11 g11_d12 g11_d13 g11_d2 g11_d22 g11_d23 g11_d3 t y0 y1 th) ![a0, a1] 1 ∧
    Gen.adj_f_s_general_22_ng_out_0_4 f0 f0_d1 f0_d2 f0_d3 f1 f1_d1 f1_d2 f1_d3 t y0 y1 a0 a1 b bu th thu
      = stratDriftTh (jet_general_22 f0 f0_d1 f0_d2 f0_d3 f1 f1_d1 f1_d2 f1_d3 g00 g00_d1 g00_d11 g00_d12 g00_d13 g00_d2 g00_d22 g00_d23 g00_d3 g01 g01_d1 g01_d11 g01_d12 g01_d13 g01_d2 g01_d22 g01_d23 g01_d3 g10 g10_d1 g10_d11 g10_d12 g10_d13 g10_d2 g10_d22 g10_d23 g10_d3 g11 g11_d1 g11_d11 g11_d12 g11_d13 g11_d2 g11_d22 g11_d23 g11_d3 t y0 y1 th) ![a0, a1] 0 ∧
    Gen.adj_f_s_general_22_ng_out_0_5 f0 f0_d1 f0_d2 f0_d3 f1 f1_d1 f1_d2 f1_d3 t y0 y1 a0 a1 b bu th thu
      = stratDriftTh (jet_general_22 f0 f0_d1 f0_d2 f0_d3 f1 f1_d1 f1_d2 f1_d3 g00 g00_d1 g00_d11 g00_d12 g00_d13 g00_d2 g00_d22 g00_d23 g00_d3 g01 g01_d1 g01_d11 g01_d12 g01_d13 g01_d2 g01_d22 g01_d23 g01_d3 g10 g10_d1 g10_d11 g10_d12 g10_d13 g10_d2 g10_d22 g10_d23 g10_d3 g11 g11_d1 g11_d11 g11_d12 g11_d13 g11_d2 g11_d22 g11_d23 g11_d3 t y0 y1 th) ![a0, a1] 1 := by
  refine ⟨?_, ?_, ?_, ?_, ?_, ?_⟩ <;>
  simp [Gen.adj_f_s_general_22_ng_out_0_0, Gen.adj_f_s_general_22_ng_out_0_1, Gen.adj_f_s_general_22_ng_out_0_2, Gen.adj_f_s_general_22_ng_out_0_3, Gen.adj_f_s_general_22_ng_out_0_4, Gen.adj_f_s_general_22_ng_out_0_5, jet_general_22, stratDriftY, stratDriftA, stratDriftTh, itoDriftY, itoDriftA, itoDriftTh, gProdY, gProdA, gProdTh, gdgY, gdgA, gdgTh, driftY, driftA, driftTh, diffY, diffA, diffTh, itoCorr, itoCorrY, itoCorrTh, fStrat, fStratY, fStratTh, colCorrY, colCorrA, colCorrTh, Fin.sum_univ_two, Fin.sum_univ_one, Fin.isValue, Matrix.cons_val_zero, Matrix.cons_val_one, Matrix.cons_val_fin_one, Matrix.head_cons] <;> ring

theorem adj_f_s_general_22_ng_unused_param_zero (f0 : K → K → K → K → K) (f0_d1 : K → K → K → K → K) (f0_d2 : K → K → K → K → K) (f0_d3 : K → K → K → K → K) (f1 : K → K → K → K → K) (f1_d1 : K → K → K → K → K) (f1_d2 : K → K → K → K → K) (f1_d3 : K → K → K → K → K) (g00 : K → K → K → K → K) (g00_d1 : K → K → K → K → K) (g00_d11 : K → K → K → K → K) (g00_d12 : K → K → K → K → K) (g00_d13 : K → K → K → K → K) (g00_d2 : K → K → K → K → K) (g00_d22 : K → K → K → K → K) (g00_d23 : K → K → K → K → K) (g00_d3 : K → K → K → K → K) (g01 : K → K → K → K → K) (g01_d1 : K → K → K → K → K) (g01_d11 : K → K → K → K → K) (g01_d12 : K → K → K → K → K) (g01_d13 : K → K → K → K → K) (g01_d2 : K → K → K → K → K) (g01_d22 : K → K → K → K → K) (g01_d23 : K → K → K → K → K) (g01_d3 : K → K → K → K → K) (g10 : K → K → K → K → K) (g10_d1 : K → K → K → K → K) (g10_d11 : K → K → K → K → K) (g10_d12 : K → K → K → K → K) (g10_d13 : K → K → K → K → K) (g10_d2 : K → K → K → K → K) (g10_d22 : K → K → K → K → K) (g10_d23 : K → K → K → K → K) (g10_d3 : K → K → K → K → K) (g11 : K → K → K → K → K) (g11_d1 : K → K → K → K → K) (g11_d11 : K → K → K → K → K) (g11_d12 : K → K → K → K → K) (g11_d13 : K → K → K → K → K) (g11_d2 : K → K → K → K → K) (g11_d22 : K → K → K → K → K) (g11_d23 : K → K → K → K → K) (g11_d3 : K → K → K → K → K) (t y0 y1 a0 a1 b bu th thu : K) :
    Gen.adj_f_s_general_22_ng_out_0_5 f0 f0_d1 f0_d2 f0_d3 f1 f1_d1 f1_d2 f1_d3 t y0 y1 a0 a1 b bu th thu = 0 := by
  simp [Gen.adj_f_s_general_22_ng_out_0_5]

theorem adj_f_s_general_22_ng_graph (f0 : K → K → K → K → K) (f0_d1 : K → K → K → K → K) (f0_d2 : K → K → K → K → K) (f0_d3 : K → K → K → K → K) (f1 : K → K → K → K → K) (f1_d1 : K → K → K → K → K) (f1_d2 : K → K → K → K → K) (f1_d3 : K → K → K → K → K) (g00 : K → K → K → K → K) (g00_d1 : K → K → K → K → K) (g00_d11 : K → K → K → K → K) (g00_d12 : K → K → K → K → K) (g00_d13 : K → K → K → K → K) (g00_d2 : K → K → K → K → K) (g00_d22 : K → K → K → K → K) (g00_d23 : K → K → K → K → K) (g00_d3 : K → K → K → K → K) (g01 : K → K → K → K → K) (g01_d1 : K → K → K → K → K) (g01_d11 : K → K → K → K → K) (g01_d12 : K → K → K → K → K) (g01_d13 : K → K → K → K → K) (g01_d2 : K → K → K → K → K) (g01_d22 : K → K → K → K → K) (g01_d23 : K → K → K → K → K) (g01_d3 : K → K → K → K → K) (g10 : K → K → K → K → K) (g10_d1 : K → K → K → K → K) (g10_d11 : K → K → K → K → K) (g10_d12 : K → K → K → K → K) (g10_d13 : K → K → K → K → K) (g10_d2 : K → K → K → K → K) (g10_d22 : K → K → K → K → K) (g10_d23 : K → K → K → K → K) (g10_d3 : K → K → K → K → K) (g11 : K → K → K → K → K) (g11_d1 : K → K → K → K → K) (g11_d11 : K → K → K → K → K) (g11_d12 : K → K → K → K → K) (g11_d13 : K → K → K → K → K) (g11_d2 : K → K → K → K → K) (g11_d22 : K → K → K → K → K) (g11_d23 : K → K → K → K → K) (g11_d3 : K → K → K → K → K) (t y0 y1 a0 a1 b bu th thu : K) :
    Gen.adj_f_s_general_22_ng_rg_out f0 f0_d1 f0_d2 f0_d3 f1 f1_d1 f1_d2 f1_d3 t y0 y1 a0 a1 b bu th thu = 0 ∧
    Gen.adj_f_s_general_22_ng_leaf_out f0 f0_d1 f0_d2 f0_d3 f1 f1_d1 f1_d2 f1_d3 t y0 y1 a0 a1 b bu th thu = 1 ∧
    Gen.adj_f_s_general_22_ng_rg_z_after f0 f0_d1 f0_d2 f0_d3 f1 f1_d1 f1_d2 f1_d3 t y0 y1 a0 a1 b bu th thu = 0 ∧
    Gen.adj_f_s_general_22_ng_leaf_z_after f0 f0_d1 f0_d2 f0_d3 f1 f1_d1 f1_d2 f1_d3 t y0 y1 a0 a1 b bu th thu = 1 := by
  refine ⟨?_, ?_, ?_, ?_⟩ <;> simp only [Gen.adj_f_s_general_22_ng_rg_out, Gen.adj_f_s_general_22_ng_leaf_out, Gen.adj_f_s_general_22_ng_rg_z_after, Gen.adj_f_s_general_22_ng_leaf_z_after]

theorem adj_f_s_general_22_en_spec (f0 : K → K → K → K → K) (f0_d1 : K → K → K → K → K) (f0_d2 : K → K → K → K → K) (f0_d3 : K → K → K → K → K) (f1 : K → K → K → K → K) (f1_d1 : K → K → K → K → K) (f1_d2 : K → K → K → K → K) (f1_d3 : K → K → K → K → K) (g00 : K → K → K → K → K) (g00_d1 : K → K → K → K → K) (g00_d11 : K → K → K → K → K) (g00_d12 : K → K → K → K → K) (g00_d13 : K → K → K → K → K) (g00_d2 : K → K → K → K → K) (g00_d22 : K → K → K → K → K) (g00_d23 : K → K → K → K → K) (g00_d3 : K → K → K → K → K) (g01 : K → K → K → K → K) (g01_d1 : K → K → K → K → K) (g01_d11 : K → K → K → K → K) (g01_d12 : K → K → K → K → K) (g01_d13 : K → K → K → K → K) (g01_d2 : K → K → K → K → K) (g01_d22 : K → K → K → K → K) (g01_d23 : K → K → K → K → K) (g01_d3 : K → K → K → K → K) (g10 : K → K → K → K → K) (g10_d1 : K → K → K → K → K) (g10_d11 : K → K → K → K → K) (g10_d12 : K → K → K → K → K) (g10_d13 : K → K → K → K → K) (g10_d2 : K → K → K → K → K) (g10_d22 : K → K → K → K → K) (g10_d23 : K → K → K → K → K) (g10_d3 : K → K → K → K → K) (g11 : K → K → K → K → K) (g11_d1 : K → K → K → K → K) (g11_d11 : K → K → K → K → K) (g11_d12 : K → K → K → K → K) (g11_d13 : K → K → K → K → K) (g11_d2 : K → K → K → K → K) (g11_d22 : K → K → K → K → K) (g11_d23 : K → K → K → K → K) (g11_d3 : K → K → K → K → K) (t y0 y1 a0 a1 b bu th thu : K) :
    Gen.adj_f_s_general_22_en_out_0_0 f0 f0_d1 f0_d2 f0_d3 f1 f1_d1 f1_d2 f1_d3 t y0 y1 a0 a1 b bu th thu
      = stratDriftY (jet_general_22 f0 f0_d1 f0_d2 f0_d3 f1 f1_d1 f1_d2 f1_d3 g00 g00_d1 g00_d11 g00_d12 g00_d13 g00_d2 g00_d22 g00_d23 g00_d3 g01 g01_d1 g01_d11 g01_d12 g01_d13 g01_d2 g01_d22 g01_d23 g01_d3 g10 g10_d1 g10_d11 g10_d12 g10_d13 g10_d2 g10_d22 g10_d23 g10_d3 g11 g11_d1 g11_d11 g11_d12 g11_d13 g11_d2 g11_d22 g11_d23 g11_d3 t y0 y1 th) 0 ∧
    Gen.adj_f_s_general_22_en_out_0_1 f0 f0_d1 f0_d2 f0_d3 f1 f1_d1 f1_d2 f1_d3 t y0 y1 a0 a1 b bu th thu
      = stratDriftY (jet_general_22 f0 f0_d1 f0_d2 f0_d3 f1 f1_d1 f1_d2 f1_d3 g00 g00_d1 g00_d11 g00_d12 g00_d13 g00_d2 g00_d22 g00_d23 g00_d3 g01 g01_d1 g01_d11 g01_d12 g01_d13 g01_d2 g01_d22 g01_d23 g01_d3 g10 g10_d1 g10_d11 g10_d12 g10_d13 g10_d2 g10_d22 g10_d23 g10_d3 g11 g11_d1 g11_d11 g11_d12 g11_d13 g11_d2 g11_d22 g11_d23 g11_d3 t y0 y1 th) 1 ∧
    Gen.adj_f_s_general_22_en_out_0_2 f0 f0_d1 f0_d2 f0_d3 f1 f1_d1 f1_d2 f1_d3 t y0 y1 a0 a1 b bu th thu
      = stratDriftA (jet_general_22 f0 f0_d1 f0_d2 f0_d3 f1 f1_d1 f1_d2 f1_d3 g00 g00_d1 g00_d11 g00_d12 g00_d13 g00_d2 g00_d22 g00_d23 g00_d3 g01 g01_d1 g01_d11 g01_d12 g01_d13 g01_d2 g01_d22 g01_d23 g01_d3 g10 g10_d1 g10_d11 g10_d12 g10_d13 g10_d2 g10_d22 g10_d23 g10_d3 g11 g11_d1 g11_d11 g11_d12 g11_d13 g11_d2 g11_d22 g11_d23 g11_d3 t y0 y1 th) ![a0, a1] 0 ∧
    Gen.adj_f_s_general_22_en_out_0_3 f0 f0_d1 f0_d2 f0_d3 f1 f1_d1 f1_d2 f1_d3 t y0 y1 a0 a1 b bu th thu
      = stratDriftA (jet_general_22 f0 f0_d1 f0_d2 f0_d3 f1 f1_d1 f1_d2 f1_d3 g00 g00_d1 g00_d11 g00_d12 g00_d13 g00_d2 g00_d22 g00_d23 g00_d3 g01 g01_d1 g01_d11 g01_d12 g01_d13 g01_d2 g01_d22 g01_d23 g01_d3 g10 g10_d1 g10_d11 g10_d12 g10_d13 g10_d2 g10_d22 g10_d23 g10_d3 g11 g11_d1 g11_d11 g11_d12 g11_d13 g11_d2 g11_d22 g11_d23 g11_d3 t y0 y1 th) ![a0, a1] 1 ∧
    Gen.adj_f_s_general_22_en_out_0_4 f0 f0_d1 f0_d2 f0_d3 f1 f1_d1 f1_d2 f1_d3 t y0 y1 a0 a1 b bu th thu
      = stratDriftTh (jet_general_22 f0 f0_d1 f0_d2 f0_d3 f1 f1_d1 f1_d2 f1_d3 g00 g00_d1 g00_d11 g00_d12 g00_d13 g00_d2 g00_d22 g00_d23 g00_d3 g01 g01_d1 g01_d11 g01_d12 g01_d13 g01_d2 g01_d22 g01_d23 g01_d3 g10 g10_d1 g10_d11 g10_d12 g10_d13 g10_d2 g10_d22 g10_d23 g10_d3 g11 g11_d1 g11_d11 g11_d12 g11_d13 g11_d2 g11_d22 g11_d23 g11_d3 t y0 y1 th) ![a0, a1] 0 ∧
    Gen.adj_f_s_general_22_en_out_0_5 f0 f0_d1 f0_d2 f0_d3 f1 f1_d1 f1_d2 f1_d3 t y0 y1 a0 a1 b bu th thu
      = stratDriftTh (jet_general_22 f0 f0_d1 f0_d2 f0_d3 f1 f1_d1 f1_d2 f1_d3 g00 g00_d1 g00_d11 g00_d12 g00_d13 g00_d2 g00_d22 g00_d23 g00_d3 g01 g01_d1 g01_d11 g01_d12 g01_d13 g01_d2 g01_d22 g01_d23 g01_d3 g10 g10_d1 g10_d11 g10_d12 g10_d13 g10_d2 g10_d22 g10_d23 g10_d3 g11 g11_d1 g11_d11 g11_d12 g11_d13 g11_d2 g11_d22 g11_d23 g11_d3 t y0 y1 th) ![a0, a1] 1 := by
  refine ⟨?_, ?_, ?_, ?_, ?_, ?_⟩ <;>
  simp [Gen.adj_f_s_general_22_en_out_0_0, Gen.adj_f_s_general_22_en_out_0_1, Gen.adj_f_s_general_22_en_out_0_2, Gen.adj_f_s_general_22_en_out_0_3, Gen.adj_f_s_general_22_en_out_0_4, Gen.adj_f_s_general_22_en_out_0_5, jet_general_22, stratDriftY, stratDriftA, stratDriftTh, itoDriftY, itoDriftA, itoDriftTh, gProdY, gProdA, gProdTh, gdgY, gdgA, gdgTh, driftY, driftA, driftTh, diffY, diffA, diffTh, itoCorr, itoCorrY, itoCorrTh, fStrat, fStratY, fStratTh, colCorrY, colCorrA, colCorrTh, Fin.sum_univ_two, Fin.sum_univ_one, Fin.isValue, Matrix.cons_val_zero, Matrix.cons_val_one, Matrix.cons_val_fin_one, Matrix.head_cons] <;> ring

theorem adj_f_s_general_22_en_unused_param_zero (f0 : K → K → K → K → K) (f0_d1 : K → K → K → K → K) (f0_d2 : K → K → K → K → K) (f0_d3 : K → K → K → K → K) (f1 : K → K → K → K → K) (f1_d1 : K → K → K → K → K) (f1_d2 : K → K → K → K → K) (f1_d3 : K → K → K → K → K) (g00 : K → K → K → K → K) (g00_d1 : K → K → K → K → K) (g00_d11 : K → K → K → K → K) (g00_d12 : K → K → K → K → K) (g00_d13 : K → K → K → K → K) (g00_d2 : K → K → K → K → K) (g00_d22 : K → K → K → K → K) (g00_d23 : K → K → K → K → K) (g00_d3 : K → K → K → K → K) (g01 : K → K → K → K → K) (g01_d1 : K → K → K → K → K) (g01_d11 : K → K → K → K → K) (g01_d12 : K → K → K → K → K) (g01_d13 : K → K → K → K → K) (g01_d2 : K → K → K → K → K) (g01_d22 : K → K → K → K → K) (g01_d23 : K → K → K → K → K) (g01_d3 : K → K → K → K → K) (g10 : K → K → K → K → K) (g10_d1 : K → K → K → K → K) (g10_d11 : K → K → K → K → K) (g10_d12 : K → K → K → K → K) (g10_d13 : K → K → K → K → K) (g10_d2 : K → K → K → K → K) (g10_d22 : K → K → K → K → K) (g10_d23 : K → K → K → K → K) (g10_d3 : K → K → K → K → K) (g11 : K → K → K → K → K) (g11_d1 : K → K → K → K → K) (g11_d11 : K → K → K → K → K) (g11_d12 : K → K → K → K → K) (g11_d13 : K → K → K → K → K) (g11_d2 : K → K → K → K → K) (g11_d22 : K → K → K → K → K) (g11_d23 : K → K → K → K → K) (g11_d3 : K → K → K → K → K) (t y0 y1 a0 a1 b bu th thu : K) :
    Gen.adj_f_s_general_22_en_out_0_5 f0 f0_d1 f0_d2 f0_d3 f1 f1_d1 f1_d2 f1_d3 t y0 y1 a0 a1 b bu th thu = 0 := by
  simp [Gen.adj_f_s_general_22_en_out_0_5]

theorem adj_f_s_general_22_en_graph (f0 : K → K → K → K → K) (f0_d1 : K → K → K → K → K) (f0_d2 : K → K → K → K → K) (f0_d3 : K → K → K → K → K) (f1 : K → K → K → K → K) (f1_d1 : K → K → K → K → K) (f1_d2 : K → K → K → K → K) (f1_d3 : K → K → K → K → K) (g00 : K → K → K → K → K) (g00_d1 : K → K → K → K → K) (g00_d11 : K → K → K → K → K) (g00_d12 : K → K → K → K → K) (g00_d13 : K → K → K → K → K) (g00_d2 : K → K → K → K → K) (g00_d22 : K → K → K → K → K) (g00_d23 : K → K → K → K → K) (g00_d3 : K → K → K → K → K) (g01 : K → K → K → K → K) (g01_d1 : K → K → K → K → K) (g01_d11 : K → K → K → K → K) (g01_d12 : K → K → K → K → K) (g01_d13 : K → K → K → K → K) (g01_d2 : K → K → K → K → K) (g01_d22 : K → K → K → K → K) (g01_d23 : K → K → K → K → K) (g01_d3 : K → K → K → K → K) (g10 : K → K → K → K → K) (g10_d1 : K → K → K → K → K) (g10_d11 : K → K → K → K → K) (g10_d12 : K → K → K → K → K) (g10_d13 : K → K → K → K → K) (g10_d2 : K → K → K → K → K) (g10_d22 : K → K → K → K → K) (g10_d23 : K → K → K → K → K) (g10_d3 : K → K → K → K → K) (g11 : K → K → K → K → K) (g11_d1 : K → K → K → K → K) (g11_d11 : K → K → K → K → K) (g11_d12 : K → K → K → K → K) (g11_d13 : K → K → K → K → K) (g11_d2 : K → K → K → K → K) (g11_d22 : K → K → K → K → K) (g11_d23 : K → K → K → K → K) (g11_d3 : K → K → K → K → K) (t y0 y1 a0 a1 b bu th thu : K) :
    Gen.adj_f_s_general_22_en_rg_out f0 f0_d1 f0_d2 f0_d3 f1 f1_d1 f1_d2 f1_d3 t y0 y1 a0 a1 b bu th thu = 1 ∧
    Gen.adj_f_s_general_22_en_leaf_out f0 f0_d1 f0_d2 f0_d3 f1 f1_d1 f1_d2 f1_d3 t y0 y1 a0 a1 b bu th thu = 0 ∧
    Gen.adj_f_s_general_22_en_rg_z_after f0 f0_d1 f0_d2 f0_d3 f1 f1_d1 f1_d2 f1_d3 t y0 y1 a0 a1 b bu th thu = 1 ∧
    Gen.adj_f_s_general_22_en_leaf_z_after f0 f0_d1 f0_d2 f0_d3 f1 f1_d1 f1_d2 f1_d3 t y0 y1 a0 a1 b bu th thu = 1 := by
  refine ⟨?_, ?_, ?_, ?_⟩ <;> simp only [Gen.adj_f_s_general_22_en_rg_out, Gen.adj_f_s_general_22_en_leaf_out, Gen.adj_f_s_general_22_en_rg_z_after, Gen.adj_f_s_general_22_en_leaf_z_after]

theorem adj_gp_s_general_22_ng_spec (f0 : K → K → K → K → K) (f0_d1 : K → K → K → K → K) (f0_d2 : K → K → K → K → K) (f0_d3 : K → K → K → K → K) (f1 : K → K → K → K → K) (f1_d1 : K → K → K → K → K) (f1_d2 : K → K → K → K → K) (f1_d3 : K → K → K → K → K) (g00 : K → K → K → K → K) (g00_d1 : K → K → K → K → K) (g00_d11 : K → K → K → K → K) (g00_d12 : K → K → K → K → K) (g00_d13 : K → K → K → K → K) (g00_d2 : K → K → K → K → K) (g00_d22 : K → K → K → K → K) (g00_d23 : K → K → K → K → K) (g00_d3 : K → K → K → K → K) (g01 : K → K → K → K → K) (g01_d1 : K → K → K → K → K) (g01_d11 : K → K → K → K → K) (g01_d12 : K → K → K → K → K) (g01_d13 : K → K → K → K → K) (g01_d2 : K → K → K → K → K) (g01_d22 : K → K → K → K → K) (g01_d23 : K → K → K → K → K) (g01_d3 : K → K → K → K → K) (g10 : K → K → K → K → K) (g10_d1 : K → K → K → K → K) (g10_d11 : K → K → K → K → K) (g10_d12 : K → K → K → K → K) (g10_d13 : K → K → K → K → K) (g10_d2 : K → K → K → K → K) (g10_d22 : K → K → K → K → K) (g10_d23 : K → K → K → K → K) (g10_d3 : K → K → K → K → K) (g11 : K → K → K → K → K) (g11_d1 : K → K → K → K → K) (g11_d11 : K → K → K → K → K) (g11_d12 : K → K → K → K → K) (g11_d13 : K → K → K → K → K) (g11_d2 : K → K → K → K → K) (g11_d22 : K → K → K → K → K) (g11_d23 : K → K → K → K → K) (g11_d3 : K → K → K → K → K) (t y0 y1 a0 a1 b bu th thu v0 v1 : K) :
    Gen.adj_gp_s_general_22_ng_out_0_0 g00 g00_d1 g00_d2 g00_d3 g01 g01_d1 g01_d2 g01_d3 g10 g10_d1 g10_d2 g10_d3 g11 g11_d1 g11_d2 g11_d3 t y0 y1 a0 a1 b bu th thu v0 v1
      = gProdY (jet_general_22 f0 f0_d1 f0_d2 f0_d3 f1 f1_d1 f1_d2 f1_d3 g00 g00_d1 g00_d11 g00_d12 g00_d13 g00_d2 g00_d22 g00_d23 g00_d3 g01 g01_d1 g01_d11 g01_d12 g01_d13 g01_d2 g01_d22 g01_d23 g01_d3 g10 g10_d1 g10_d11 g10_d12 g10_d13 g10_d2 g10_d22 g10_d23 g10_d3 g11 g11_d1 g11_d11 g11_d12 g11_d13 g11_d2 g11_d22 g11_d23 g11_d3 t y0 y1 th) ![v0, v1] 0 ∧
    Gen.adj_gp_s_general_22_ng_out_0_1 g00 g00_d1 g00_d2 g00_d3 g01 g01_d1 g01_d2 g01_d3 g10 g10_d1 g10_d2 g10_d3 g11 g11_d1 g11_d2 g11_d3 t y0 y1 a0 a1 b bu th thu v0 v1
      = gProdY (jet_general_22 f0 f0_d1 f0_d2 f0_d3 f1 f1_d1 f1_d2 f1_d3 g00 g00_d1 g00_d11 g00_d12 g00_d13 g00_d2 g00_d22 g00_d23 g00_d3 g01 g01_d1 g01_d11 g01_d12 g01_d13 g01_d2 g01_d22 g01_d23 g01_d3 g10 g10_d1 g10_d11 g10_d12 g10_d13 g10_d2 g10_d22 g10_d23 g10_d3 g11 g11_d1 g11_d11 g11_d12 g11_d13 g11_d2 g11_d22 g11_d23 g11_d3 t y0 y1 th) ![v0, v1] 1 ∧
    Gen.adj_gp_s_general_22_ng_out_0_2 g00 g00_d1 g00_d2 g00_d3 g01 g01_d1 g01_d2 g01_d3 g10 g10_d1 g10_d2 g10_d3 g11 g11_d1 g11_d2 g11_d3 t y0 y1 a0 a1 b bu th thu v0 v1
      = gProdA (jet_general_22 f0 f0_d1 f0_d2 f0_d3 f1 f1_d1 f1_d2 f1_d3 g00 g00_d1 g00_d11 g00_d12 g00_d13 g00_d2 g00_d22 g00_d23 g00_d3 g01 g01_d1 g01_d11 g01_d12 g01_d13 g01_d2 g01_d22 g01_d23 g01_d3 g10 g10_d1 g10_d11 g10_d12 g10_d13 g10_d2 g10_d22 g10_d23 g10_d3 g11 g11_d1 g11_d11 g11_d12 g11_d13 g11_d2 g11_d22 g11_d23 g11_d3 t y0 y1 th) ![a0, a1] ![v0, v1] 0 ∧
    Gen.adj_gp_s_general_22_ng_out_0_3 g00 g00_d1 g00_d2 g00_d3 g01 g01_d1 g01_d2 g01_d3 g10 g10_d1 g10_d2 g10_d3 g11 g11_d1 g11_d2 g11_d3 t y0 y1 a0 a1 b bu th thu v0 v1
      = gProdA (jet_general_22 f0 f0_d1 f0_d2 f0_d3 f1 f1_d1 f1_d2 f1_d3 g00 g00_d1 g00_d11 g00_d12 g00_d13 g00_d2 g00_d22 g00_d23 g00_d3 g01 g01_d1 g01_d11 g01_d12 g01_d13 g01_d2 g01_d22 g01_d23 g01_d3 g10 g10_d1 g10_d11 g10_d12 g10_d13 g10_d2 g10_d22 g10_d23 g10_d3 g11 g11_d1 g11_d11 g11_d12 g11_d13 g11_d2 g11_d22 g11_d23 g11_d3 t y0 y1 th) ![a0, a1] ![v0, v1] 1 ∧
    Gen.adj_gp_s_general_22_ng_out_0_4 g00 g00_d1 g00_d2 g00_d3 g01 g01_d1 g01_d2 g01_d3 g10 g10_d1 g10_d2 g10_d3 g11 g11_d1 g11_d2 g11_d3 t y0 y1 a0 a1 b bu th thu v0 v1
      = gProdTh (jet_general_22 f0 f0_d1 f0_d2 f0_d3 f1 f1_d1 f1_d2 f1_d3 g00 g00_d1 g00_d11 g00_d12 g00_d13 g00_d2 g00_d22 g00_d23 g00_d3 g01 g01_d1 g01_d11 g01_d12 g01_d13 g01_d2 g01_d22 g01_d23 g01_d3 g10 g10_d1 g10_d11 g10_d12 g10_d13 g10_d2 g10_d22 g10_d23 g10_d3 g11 g11_d1 g11_d11 g11_d12 g11_d13 g11_d2 g11_d22 g11_d23 g11_d3 t y0 y1 th) ![a0, a1] ![v0, v1] 0 ∧
    Gen.adj_gp_s_general_22_ng_out_0_5 g00 g00_d1 g00_d2 g00_d3 g01 g01_d1 g01_d2 g01_d3 g10 g10_d1 g10_d2 g10_d3 g11 g11_d1 g11_d2 g11_d3 t y0 y1 a0 a1 b bu th thu v0 v1
      = gProdTh (jet_general_22 f0 f0_d1 f0_d2 f0_d3 f1 f1_d1 f1_d2 f1_d3 g00 g00_d1 g00_d11 g00_d12 g00_d13 g00_d2 g00_d22 g00_d23 g00_d3 g01 g01_d1 g01_d11 g01_d12 g01_d13 g01_d2 g01_d22 g01_d23 g01_d3 g10 g10_d1 g10_d11 g10_d12 g10_d13 g10_d2 g10_d22 g10_d23 g10_d3 g11 g11_d1 g11_d11 g11_d12 g11_d13 g11_d2 g11_d22 g11_d23 g11_d3 t y0 y1 th) ![a0, a1] ![v0, v1] 1 := by
  refine ⟨?_, ?_, ?_, ?_, ?_, ?_⟩ <;>
  simp [Gen.adj_gp_s_general_22_ng_out_0_0, Gen.adj_gp_s_general_22_ng_out_0_1, Gen.adj_gp_s_general_22_ng_out_0_2, Gen.adj_gp_s_general_22_ng_out_0_3, Gen.adj_gp_s_general_22_ng_out_0_4, Gen.adj_gp_s_general_22_ng_out_0_5, jet_general_22, stratDriftY, stratDriftA, stratDriftTh, itoDriftY, itoDriftA, itoDriftTh, gProdY, gProdA, gProdTh, gdgY, gdgA, gdgTh, driftY, driftA, driftTh, diffY, diffA, diffTh, itoCorr, itoCorrY, itoCorrTh, fStrat, fStratY, fStratTh, colCorrY, colCorrA, colCorrTh, Fin.sum_univ_two, Fin.sum_univ_one, Fin.isValue, Matrix.cons_val_zero, Matrix.cons_val_one, Matrix.cons_val_fin_one, Matrix.head_cons] <;> ring

theorem adj_gp_s_general_22_ng_unused_param_zero (f0 : K → K → K → K → K) (f0_d1 : K → K → K → K → K) (f0_d2 : K → K → K → K → K) (f0_d3 : K → K → K → K → K) (f1 : K → K → K → K → K) (f1_d1 : K → K → K → K → K) (f1_d2 : K → K → K → K → K) (f1_d3 : K → K → K → K → K) (g00 : K → K → K → K → K) (g00_d1 : K → K → K → K → K) (g00_d11 : K → K → K → K → K) (g00_d12 : K → K → K → K → K) (g00_d13 : K → K → K → K → K) (g00_d2 : K → K → K → K → K) (g00_d22 : K → K → K → K → K) (g00_d23 : K → K → K → K → K) (g00_d3 : K → K → K → K → K) (g01 : K → K → K → K → K) (g01_d1 : K → K → K → K → K) (g01_d11 : K → K → K → K → K) (g01_d12 : K → K → K → K → K) (g01_d13 : K → K → K → K → K) (g01_d2 : K → K → K → K → K) (g01_d22 : K → K → K → K → K) (g01_d23 : K → K → K → K → K) (g01_d3 : K → K → K → K → K) (g10 : K → K → K → K → K) (g10_d1 : K → K → K → K → K) (g10_d11 : K → K → K → K → K) (g10_d12 : K → K → K → K → K) (g10_d13 : K → K → K → K → K) (g10_d2 : K → K → K → K → K) (g10_d22 : K → K → K → K → K) (g10_d23 : K → K → K → K → K) (g10_d3 : K → K → K → K → K) (g11 : K → K → K → K → K) (g11_d1 : K → K → K → K → K) (g11_d11 : K → K → K → K → K) (g11_d12 : K → K → K → K → K) (g11_d13 : K → K → K → K → K) (g11_d2 : K → K → K → K → K) (g11_d22 : K → K → K → K → K) (g11_d23 : K → K → K → K → K) (g11_d3 : K → K → K → K → K) (t y0 y1 a0 a1 b bu th thu v0 v1 : K) :
    Gen.adj_gp_s_general_22_ng_out_0_5 g00 g00_d1 g00_d2 g00_d3 g01 g01_d1 g01_d2 g01_d3 g10 g10_d1 g10_d2 g10_d3 g11 g11_d1 g11_d2 g11_d3 t y0 y1 a0 a1 b bu th thu v0 v1 = 0 := by
  simp [Gen.adj_gp_s_general_22_ng_out_0_5]

theorem adj_gp_s_general_22_ng_graph (f0 : K → K → K → K → K) (f0_d1 : K → K → K → K → K) (f0_d2 : K → K → K → K → K) (f0_d3 : K → K → K → K → K) (f1 : K → K → K → K → K) (f1_d1 : K → K → K → K → K) (f1_d2 : K → K → K → K → K) (f1_d3 : K → K → K → K → K) (g00 : K → K → K → K → K) (g00_d1 : K → K → K → K → K) (g00_d11 : K → K → K → K → K) (g00_d12 : K → K → K → K → K) (g00_d13 : K → K → K → K → K) (g00_d2 : K → K → K → K → K) (g00_d22 : K → K → K → K → K) (g00_d23 : K → K → K → K → K) (g00_d3 : K → K → K → K → K) (g01 : K → K → K → K → K) (g01_d1 : K → K → K → K → K) (g01_d11 : K → K → K → K → K) (g01_d12 : K → K → K → K → K) (g01_d13 : K → K → K → K → K) (g01_d2 : K → K → K → K → K) (g01_d22 : K → K → K → K → K) (g01_d23 : K → K → K → K → K) (g01_d3 : K → K → K → K → K) (g10 : K → K → K → K → K) (g10_d1 : K → K → K → K → K) (g10_d11 : K → K → K → K → K) (g10_d12 : K → K → K → K → K) (g10_d13 : K → K → K → K → K) (g10_d2 : K → K → K → K → K) (g10_d22 : K → K → K → K → K) (g10_d23 : K → K → K → K → K) (g10_d3 : K → K → K → K → K) (g11 : K → K → K → K → K) (g11_d1 : K → K → K → K → K) (g11_d11 : K → K → K → K → K) (g11_d12 : K → K → K → K → K) (g11_d13 : K → K → K → K → K) (g11_d2 : K → K → K → K → K) (g11_d22 : K → K → K → K → K) (g11_d23 : K → K → K → K → K) (g11_d3 : K → K → K → K → K) (t y0 y1 a0 a1 b bu th thu v0 v1 : K) :
    Gen.adj_gp_s_general_22_ng_rg_out g00 g00_d1 g00_d2 g00_d3 g01 g01_d1 g01_d2 g01_d3 g10 g10_d1 g10_d2 g10_d3 g11 g11_d1 g11_d2 g11_d3 t y0 y1 a0 a1 b bu th thu v0 v1 = 0 ∧
    Gen.adj_gp_s_general_22_ng_leaf_out g00 g00_d1 g00_d2 g00_d3 g01 g01_d1 g01_d2 g01_d3 g10 g10_d1 g10_d2 g10_d3 g11 g11_d1 g11_d2 g11_d3 t y0 y1 a0 a1 b bu th thu v0 v1 = 1 ∧
    Gen.adj_gp_s_general_22_ng_rg_z_after g00 g00_d1 g00_d2 g00_d3 g01 g01_d1 g01_d2 g01_d3 g10 g10_d1 g10_d2 g10_d3 g11 g11_d1 g11_d2 g11_d3 t y0 y1 a0 a1 b bu th thu v0 v1 = 0 ∧
    Gen.adj_gp_s_general_22_ng_leaf_z_after g00 g00_d1 g00_d2 g00_d3 g01 g01_d1 g01_d2 g01_d3 g10 g10_d1 g10_d2 g10_d3 g11 g11_d1 g11_d2 g11_d3 t y0 y1 a0 a1 b bu th thu v0 v1 = 1 := by
  refine ⟨?_, ?_, ?_, ?_⟩ <;> simp only [Gen.adj_gp_s_general_22_ng_rg_out, Gen.adj_gp_s_general_22_ng_leaf_out, Gen.adj_gp_s_general_22_ng_rg_z_after, Gen.adj_gp_s_general_22_ng_leaf_z_after]

theorem adj_gp_s_general_22_en_spec (f0 : K → K → K → K → K) (f0_d1 : K → K → K → K → K) (f0_d2 : K → K → K → K → K) (f0_d3 : K → K → K → K → K) (f1 : K → K → K → K → K) (f1_d1 : K → K → K → K → K) (f1_d2 : K → K → K → K → K) (f1_d3 : K → K → K → K → K) (g00 : K → K → K → K → K) (g00_d1 : K → K → K → K → K) (g00_d11 : K → K → K → K → K) (g00_d12 : K → K → K → K → K) (g00_d13 : K → K → K → K → K) (g00_d2 : K → K → K → K → K) (g00_d22 : K → K → K → K → K) (g00_d23 : K → K → K → K → K) (g00_d3 : K → K → K → K → K) (g01 : K → K → K → K → K) (g01_d1 : K → K → K → K → K) (g01_d11 : K → K → K → K → K) (g01_d12 : K → K → K → K → K) (g01_d13 : K → K → K → K → K) (g01_d2 : K → K → K → K → K) (g01_d22 : K → K → K → K → K) (g01_d23 : K → K → K → K → K) (g01_d3 : K → K → K → K → K) (g10 : K → K → K → K → K) (g10_d1 : K → K → K → K → K) (g10_d11 : K → K → K → K → K) (g10_d12 : K → K → K → K → K) (g10_d13 : K → K → K → K → K) (g10_d2 : K → K → K → K → K) (g10_d22 : K → K → K → K → K) (g10_d23 : K → K → K → K → K) (g10_d3 : K → K → K → K → K) (g11 : K → K → K → K → K) (g11_d1 : K → K → K → K → K) (g11_d11 : K → K → K → K → K) (g11_d12 : K → K → K → K → K) (g11_d13 : K → K → K → K → K) (g11_d2 : K → K → K → K → K) (g11_d22 : K → K → K → K → K) (g11_d23 : K → K → K → K → K) (g11_d3 : K → K → K → K → K) (t y0 y1 a0 a1 b bu th thu v0 v1 : K) :
    Gen.adj_gp_s_general_22_en_out_0_0 g00 g00_d1 g00_d2 g00_d3 g01 g01_d1 g01_d2 g01_d3 g10 g10_d1 g10_d2 g10_d3 g11 g11_d1 g11_d2 g11_d3 t y0 y1 a0 a1 b bu th thu v0 v1
      = gProdY (jet_general_22 f0 f0_d1 f0_d2 f0_d3 f1 f1_d1 f1_d2 f1_d3 g00 g00_d1 g00_d11 g00_d12 g00_d13 g00_d2 g00_d22 g00_d23 g00_d3 g01 g01_d1 g01_d11 g01_d12 g01_d13 g01_d2 g01_d22 g01_d23 g01_d3 g10 g10_d1 g10_d11 g10_d12 g10_d13 g10_d2 g10_d22 g10_d23 g10_d3 g11 g11_d1 g11_d11 g11_d12 g11_d13 g11_d2 g11_d22 g11_d23 g11_d3 t y0 y1 th) ![v0, v1] 0 ∧
    Gen.adj_gp_s_general_22_en_out_0_1 g00 g00_d1 g00_d2 g00_d3 g01 g01_d1 g01_d2 g01_d3 g10 g10_d1 g10_d2 g10_d3 g11 g11_d1 g11_d2 g11_d3 t y0 y1 a0 a1 b bu th thu v0 v1
      = gProdY (jet_general_22 f0 f0_d1 f0_d2 f0_d3 f1 f1_d1 f1_d2 f1_d3 g00 g00_d1 g00_d11 g00_d12 g00_d13 g00_d2 g00_d22 g00_d23 g00_d3 g01 g01_d1 g01_d11 g01_d12 g01_d13 g01_d2 g01_d22 g01_d23 g01_d3 g10 g10_d1 g10_d11 g10_d12 g10_d13 g10_d2 g10_d22 g10_d23 g10_d3 g11 g11_d1 g11_d11 g11_d12 g11_d13 g11_d2 g11_d22 g11_d23 g11_d3 t y0 y1 th) ![v0, v1] 1 ∧
    Gen.adj_gp_s_general_22_en_out_0_2 g00 g00_d1 g00_d2 g00_d3 g01 g01_d1 g01_d2 g01_d3 g10 g10_d1 g10_d2 g10_d3 g11 g11_d1 g11_d2 g11_d3 t y0 y1 a0 a1 b bu th thu v0 v1
      = gProdA (jet_general_22 f0 f0_d1 f0_d2 f0_d3 f1 f1_d1 f1_d2 f1_d3 g00 g00_d1 g00_d11 g00_d12 g00_d13 g00_d2 g00_d22 g00_d23 g00_d3 g01 g01_d1 g01_d11 g01_d12 g01_d13 g01_d2 g01_d22 g01_d23 g01_d3 g10 g10_d1 g10_d11 g10_d12 g10_d13 g10_d2 g10_d22 g10_d23 g10_d3 g11 g11_d1 g11_d11 g11_d12 g11_d13 g11_d2 g11_d22 g11_d23 g11_d3 t y0 y1 th) ![a0, a1] ![v0, v1] 0 ∧
    Gen.adj_gp_s_general_22_en_out_0_3 g00 g00_d1 g00_d2 g00_d3 g01 g01_d1 g01_d2 g01_d3 g10 g10_d1 g10_d2 g10_d3 g11 g11_d1 g11_d2 g11_d3 t y0 y1 a0 a1 b bu th thu v0 v1
      = gProdA (jet_general_22 f0 f0_d1 f0_d2 f0_d3 f1 f1_d1 f1_d2 f1_d3 g00 g00_d1 g00_d11 g00_d12 g00_d13 g00_d2 g00_d22 g00_d23 g00_d3 g01 g01_d1 g01_d11 g01_d12 g01_d13 g01_d2 g01_d22 g01_d23 g01_d3 g10 g10_d1 g10_d11 g10_d12 g10_d13 g10_d2 g10_d22 g10_d23 g10_d3 g11 g11_d1 g11_d11 g11_d12 g11_d13 g11_d2 g11_d22 g11_d23 g11_d3 t y0 y1 th) ![a0, a1] ![v0, v1] 1 ∧
    Gen.adj_gp_s_general_22_en_out_0_4 g00 g00_d1 g00_d2 g00_d3 g01 g01_d1 g01_d2 g01_d3 g10 g10_d1 g10_d2 g10_d3 g11 g11_d1 g11_d2 g11_d3 t y0 y1 a0 a1 b bu th thu v0 v1
      = gProdTh (jet_general_22 f0 f0_d1 f0_d2 f0_d3 f1 f1_d1 f1_d2 f1_d3 g00 g00_d1 g00_d11 g00_d12 g00_d13 g00_d2 g00_d22 g00_d23 g00_d3 g01 g01_d1 g01_d11 g01_d12 g01_d13 g01_d2 g01_d22 g01_d23 g01_d3 g10 g10_d1 g10_d11 g10_d12 g10_d13 g10_d2 g10_d22 g10_d23 g10_d3 g11 g11_d1 g11_d11 g11_d12 g11_d13 g11_d2 g11_d22 g11_d23 g11_d3 t y0 y1 th) ![a0, a1] ![v0, v1] 0 ∧
    Gen.adj_gp_s_general_22_en_out_0_5 g00 g00_d1 g00_d2 g00_d3 g01 g01_d1 g01_d2 g01_d3 g10 g10_d1 g10_d2 g10_d3 g11 g11_d1 g11_d2 g11_d3 t y0 y1 a0 a1 b bu th thu v0 v1
      = gProdTh (jet_general_22 f0 f0_d1 f0_d2 f0_d3 f1 f1_d1 f1_d2 f1_d3 g00 g00_d1 g00_d11 g00_d12 g00_d13 g00_d2 g00_d22 g00_d23 g00_d3 g01 g01_d1 g01_d11 g01_d12 g01_d13 g01_d2 g01_d22 g01_d23 g01_d3 g10 g10_d1 g10_d11 g10_d12 g10_d13 g10_d2 g10_d22 g10_d23 g10_d3 g11 g11_d1 g11_d11 g11_d12 g11_d13 g11_d2 g11_d22 g11_d23 g11_d3 t y0 y1 th) ![a0, a1] ![v0, v1] 1 := by
  refine ⟨?_, ?_, ?_, ?_, ?_, ?_⟩ <;>
  simp [Gen.adj_gp_s_general_22_en_out_0_0, Gen.adj_gp_s_general_22_en_out_0_1, Gen.adj_gp_s_general_22_en_out_0_2, Gen.adj_gp_s_general_22_en_out_0_3, Gen.adj_gp_s_general_22_en_out_0_4, Gen.adj_gp_s_general_22_en_out_0_5, jet_general_22, stratDriftY, stratDriftA, stratDriftTh, itoDriftY, itoDriftA, itoDriftTh, gProdY, gProdA, gProdTh, gdgY, gdgA, gdgTh, driftY, driftA, driftTh, diffY, diffA, diffTh, itoCorr, itoCorrY, itoCorrTh, fStrat, fStratY, fStratTh, colCorrY, colCorrA, colCorrTh, Fin.sum_univ_two, Fin.sum_univ_one, Fin.isValue, Matrix.cons_val_zero, Matrix.cons_val_one, Matrix.cons_val_fin_one, Matrix.head_cons] <;> ring

theorem adj_gp_s_general_22_en_unused_param_zero (f0 : K → K → K → K → K) (f0_d1 : K → K → K → K → K) (f0_d2 : K → K → K → K → K) (f0_d3 : K → K → K → K → K) (f1 : K → K → K → K → K) (f1_d1 : K → K → K → K → K) (f1_d2 : K → K → K → K → K) (f1_d3 : K → K → K → K → K) (g00 : K → K → K → K → K) (g00_d1 : K → K → K → K → K) (g00_d11 : K → K → K → K → K) (g00_d12 : K → K → K → K → K) (g00_d13 : K → K → K → K → K) (g00_d2 : K → K → K → K → K) (g00_d22 : K → K → K → K → K) (g00_d23 : K → K → K → K → K) (g00_d3 : K → K → K → K → K) (g01 : K → K → K → K → K) (g01_d1 : K → K → K → K → K) (g01_d11 : K → K → K → K → K) (g01_d12 : K → K → K → K → K) (g01_d13 : K → K → K → K → K) (g01_d2 : K → K → K → K → K) (g01_d22 : K → K → K → K → K) (g01_d23 : K → K → K → K → K) (g01_d3 : K → K → K → K → K) (g10 : K → K → K → K → K) (g10_d1 : K → K → K → K → K) (g10_d11 : K → K → K → K → K) (g10_d12 : K → K → K → K → K) (g10_d13 : K → K → K → K → K) (g10_d2 : K → K → K → K → K) (g10_d22 : K → K → K → K → K) (g10_d23 : K → K → K → K → K) (g10_d3 : K → K → K → K → K) (g11 : K → K → K → K → K) (g11_d1 : K → K → K → K → K) (g11_d11 : K → K → K → K → K) (g11_d12 : K → K → K → K → K) (g11_d13 : K → K → K → K → K) (g11_d2 : K → K → K → K → K) (g11_d22 : K → K → K → K → K) (g11_d23 : K → K → K → K → K) (g11_d3 : K → K → K → K → K) (t y0 y1 a0 a1 b bu th thu v0 v1 : K) :
    Gen.adj_gp_s_general_22_en_out_0_5 g00 g00_d1 g00_d2 g00_d3 g01 g01_d1 g01_d2 g01_d3 g10 g10_d1 g10_d2 g10_d3 g11 g11_d1 g11_d2 g11_d3 t y0 y1 a0 a1 b bu th thu v0 v1 = 0 := by
  simp [Gen.adj_gp_s_general_22_en_out_0_5]

theorem adj_gp_s_general_22_en_graph (f0 : K → K → K → K → K) (f0_d1 : K → K → K → K → K) (f0_d2 : K → K → K → K → K) (f0_d3 : K → K → K → K → K) (f1 : K → K → K → K → K) (f1_d1 : K → K → K → K → K) (f1_d2 : K → K → K → K → K) (f1_d3 : K → K → K → K → K) (g00 : K → K → K → K → K) (g00_d1 : K → K → K → K → K) (g00_d11 : K → K → K → K → K) (g00_d12 : K → K → K → K → K) (g00_d13 : K → K → K → K → K) (g00_d2 : K → K → K → K → K) (g00_d22 : K → K → K → K → K) (g00_d23 : K → K → K → K → K) (g00_d3 : K → K → K → K → K) (g01 : K → K → K → K → K) (g01_d1 : K → K → K → K → K) (g01_d11 : K → K → K → K → K) (g01_d12 : K → K → K → K → K) (g01_d13 : K → K → K → K → K) (g01_d2 : K → K → K → K → K) (g01_d22 : K → K → K → K → K) (g01_d23 : K → K → K → K → K) (g01_d3 : K → K → K → K → K) (g10 : K → K → K → K → K) (g10_d1 : K → K → K → K → K) (g10_d11 : K → K → K → K → K) (g10_d12 : K → K → K → K → K) (g10_d13 : K → K → K → K → K) (g10_d2 : K → K → K → K → K) (g10_d22 : K → K → K → K → K) (g10_d23 : K → K → K → K → K) (g10_d3 : K → K → K → K → K) (g11 : K → K → K → K → K) (g11_d1 : K → K → K → K → K) (g11_d11 : K → K → K → K → K) (g11_d12 : K → K → K → K → K) (g11_d13 : K → K → K → K → K) (g11_d2 : K → K → K → K → K) (g11_d22 : K → K → K → K → K) (g11_d23 : K → K → K → K → K) (g11_d3 : K → K → K → K → K) (t y0 y1 a0 a1 b bu th thu v0 v1 : K) :
    Gen.adj_gp_s_general_22_en_rg_out g00 g00_d1 g00_d2 g00_d3 g01 g01_d1 g01_d2 g01_d3 g10 g10_d1 g10_d2 g10_d3 g11 g11_d1 g11_d2 g11_d3 t y0 y1 a0 a1 b bu th thu v0 v1 = 1 ∧
    Gen.adj_gp_s_general_22_en_leaf_out g00 g00_d1 g00_d2 g00_d3 g01 g01_d1 g01_d2 g01_d3 g10 g10_d1 g10_d2 g10_d3 g11 g11_d1 g11_d2 g11_d3 t y0 y1 a0 a1 b bu th thu v0 v1 = 0 ∧
    Gen.adj_gp_s_general_22_en_rg_z_after g00 g00_d1 g00_d2 g00_d3 g01 g01_d1 g01_d2 g01_d3 g10 g10_d1 g10_d2 g10_d3 g11 g11_d1 g11_d2 g11_d3 t y0 y1 a0 a1 b bu th thu v0 v1 = 1 ∧
    Gen.adj_gp_s_general_22_en_leaf_z_after g00 g00_d1 g00_d2 g00_d3 g01 g01_d1 g01_d2 g01_d3 g10 g10_d1 g10_d2 g10_d3 g11 g11_d1 g11_d2 g11_d3 t y0 y1 a0 a1 b bu th thu v0 v1 = 1 := by
  refine ⟨?_, ?_, ?_, ?_⟩ <;> simp only [Gen.adj_gp_s_general_22_en_rg_out, Gen.adj_gp_s_general_22_en_leaf_out, Gen.adj_gp_s_general_22_en_rg_z_after, Gen.adj_gp_s_general_22_en_leaf_z_after]

theorem adj_fgp_s_general_22_ng_unused_param_zero (f0 : K → K → K → K → K) (f0_d1 : K → K → K → K → K) (f0_d2 : K → K → K → K → K) (f0_d3 : K → K → K → K → K) (f1 : K → K → K → K → K) (f1_d1 : K → K → K → K → K) (f1_d2 : K → K → K → K → K) (f1_d3 : K → K → K → K → K) (g00 : K → K → K → K → K) (g00_d1 : K → K → K → K → K) (g00_d11 : K → K → K → K → K) (g00_d12 : K → K → K → K → K) (g00_d13 : K → K → K → K → K) (g00_d2 : K → K → K → K → K) (g00_d22 : K → K → K → K → K) (g00_d23 : K → K → K → K → K) (g00_d3 : K → K → K → K → K) (g01 : K → K → K → K → K) (g01_d1 : K → K → K → K → K) (g01_d11 : K → K → K → K → K) (g01_d12 : K → K → K → K → K) (g01_d13 : K → K → K → K → K) (g01_d2 : K → K → K → K → K) (g01_d22 : K → K → K → K → K) (g01_d23 : K → K → K → K → K) (g01_d3 : K → K → K → K → K) (g10 : K → K → K → K → K) (g10_d1 : K → K → K → K → K) (g10_d11 : K → K → K → K → K) (g10_d12 : K → K → K → K → K) (g10_d13 : K → K → K → K → K) (g10_d2 : K → K → K → K → K) (g10_d22 : K → K → K → K → K) (g10_d23 : K → K → K → K → K) (g10_d3 : K → K → K → K → K) (g11 : K → K → K → K → K) (g11_d1 : K → K → K → K → K) (g11_d11 : K → K → K → K → K) (g11_d12 : K → K → K → K → K) (g11_d13 : K → K → K → K → K) (g11_d2 : K → K → K → K → K) (g11_d22 : K → K → K → K → K) (g11_d23 : K → K → K → K → K) (g11_d3 : K → K → K → K → K) (t y0 y1 a0 a1 b bu th thu v0 v1 : K) :
    Gen.adj_fgp_s_general_22_ng_f_0_5 f0 f0_d1 f0_d2 f0_d3 f1 f1_d1 f1_d2 f1_d3 g00 g00_d1 g00_d2 g00_d3 g01 g01_d1 g01_d2 g01_d3 g10 g10_d1 g10_d2 g10_d3 g11 g11_d1 g11_d2 g11_d3 t y0 y1 a0 a1 b bu th thu v0 v1 = 0 ∧
    Gen.adj_fgp_s_general_22_ng_gp_0_5 f0 f0_d1 f0_d2 f0_d3 f1 f1_d1 f1_d2 f1_d3 g00 g00_d1 g00_d2 g00_d3 g01 g01_d1 g01_d2 g01_d3 g10 g10_d1 g10_d2 g10_d3 g11 g11_d1 g11_d2 g11_d3 t y0 y1 a0 a1 b bu th thu v0 v1 = 0 := by
  refine ⟨?_, ?_⟩ <;> simp [Gen.adj_fgp_s_general_22_ng_f_0_5, Gen.adj_fgp_s_general_22_ng_gp_0_5]

theorem adj_fgp_s_general_22_ng_pair (f0 : K → K → K → K → K) (f0_d1 : K → K → K → K → K) (f0_d2 : K → K → K → K → K) (f0_d3 : K → K → K → K → K) (f1 : K → K → K → K → K) (f1_d1 : K → K → K → K → K) (f1_d2 : K → K → K → K → K) (f1_d3 : K → K → K → K → K) (g00 : K → K → K → K → K) (g00_d1 : K → K → K → K → K) (g00_d11 : K → K → K → K → K) (g00_d12 : K → K → K → K → K) (g00_d13 : K → K → K → K → K) (g00_d2 : K → K → K → K → K) (g00_d22 : K → K → K → K → K) (g00_d23 : K → K → K → K → K) (g00_d3 : K → K → K → K → K) (g01 : K → K → K → K → K) (g01_d1 : K → K → K → K → K) (g01_d11 : K → K → K → K → K) (g01_d12 : K → K → K → K → K) (g01_d13 : K → K → K → K → K) (g01_d2 : K → K → K → K → K) (g01_d22 : K → K → K → K → K) (g01_d23 : K → K → K → K → K) (g01_d3 : K → K → K → K → K) (g10 : K → K → K → K → K) (g10_d1 : K → K → K → K → K) (g10_d11 : K → K → K → K → K) (g10_d12 : K → K → K → K → K) (g10_d13 : K → K → K → K → K) (g10_d2 : K → K → K → K → K) (g10_d22 : K → K → K → K → K) (g10_d23 : K → K → K → K → K) (g10_d3 : K → K → K → K → K) (g11 : K → K → K → K → K) (g11_d1 : K → K → K → K → K) (g11_d11 : K → K → K → K → K) (g11_d12 : K → K → K → K → K) (g11_d13 : K → K → K → K → K) (g11_d2 : K → K → K → K → K) (g11_d22 : K → K → K → K → K) (g11_d23 : K → K → K → K → K) (g11_d3 : K → K → K → K → K) (t y0 y1 a0 a1 b bu th thu v0 v1 : K) :
    Gen.adj_fgp_s_general_22_ng_f_0_0 f0 f0_d1 f0_d2 f0_d3 f1 f1_d1 f1_d2 f1_d3 g00 g00_d1 g00_d2 g00_d3 g01 g01_d1 g01_d2 g01_d3 g10 g10_d1 g10_d2 g10_d3 g11 g11_d1 g11_d2 g11_d3 t y0 y1 a0 a1 b bu th thu v0 v1
      = Gen.adj_f_s_general_22_ng_out_0_0 f0 f0_d1 f0_d2 f0_d3 f1 f1_d1 f1_d2 f1_d3 t y0 y1 a0 a1 b bu th thu ∧
    Gen.adj_fgp_s_general_22_ng_f_0_1 f0 f0_d1 f0_d2 f0_d3 f1 f1_d1 f1_d2 f1_d3 g00 g00_d1 g00_d2 g00_d3 g01 g01_d1 g01_d2 g01_d3 g10 g10_d1 g10_d2 g10_d3 g11 g11_d1 g11_d2 g11_d3 t y0 y1 a0 a1 b bu th thu v0 v1
      = Gen.adj_f_s_general_22_ng_out_0_1 f0 f0_d1 f0_d2 f0_d3 f1 f1_d1 f1_d2 f1_d3 t y0 y1 a0 a1 b bu th thu ∧
    Gen.adj_fgp_s_general_22_ng_f_0_2 f0 f0_d1 f0_d2 f0_d3 f1 f1_d1 f1_d2 f1_d3 g00 g00_d1 g00_d2 g00_d3 g01 g01_d1 g01_d2 g01_d3 g10 g10_d1 g10_d2 g10_d3 g11 g11_d1 g11_d2 g11_d3 t y0 y1 a0 a1 b bu th thu v0 v1
      = Gen.adj_f_s_general_22_ng_out_0_2 f0 f0_d1 f0_d2 f0_d3 f1 f1_d1 f1_d2 f1_d3 t y0 y1 a0 a1 b bu th thu ∧
    Gen.adj_fgp_s_general_22_ng_f_0_3 f0 f0_d1 f0_d2 f0_d3 f1 f1_d1 f1_d2 f1_d3 g00 g00_d1 g00_d2 g00_d3 g01 g01_d1 g01_d2 g01_d3 g10 g10_d1 g10_d2 g10_d3 g11 g11_d1 g11_d2 g11_d3 t y0 y1 a0 a1 b bu th thu v0 v1
      = Gen.adj_f_s_general_22_ng_out_0_3 f0 f0_d1 f0_d2 f0_d3 f1 f1_d1 f1_d2 f1_d3 t y0 y1 a0 a1 b bu th thu ∧
    Gen.adj_fgp_s_general_22_ng_f_0_4 f0 f0_d1 f0_d2 f0_d3 f1 f1_d1 f1_d2 f1_d3 g00 g00_d1 g00_d2 g00_d3 g01 g01_d1 g01_d2 g01_d3 g10 g10_d1 g10_d2 g10_d3 g11 g11_d1 g11_d2 g11_d3 t y0 y1 a0 a1 b bu th thu v0 v1
      = Gen.adj_f_s_general_22_ng_out_0_4 f0 f0_d1 f0_d2 f0_d3 f1 f1_d1 f1_d2 f1_d3 t y0 y1 a0 a1 b bu th thu ∧
    Gen.adj_fgp_s_general_22_ng_f_0_5 f0 f0_d1 f0_d2 f0_d3 f1 f1_d1 f1_d2 f1_d3 g00 g00_d1 g00_d2 g00_d3 g01 g01_d1 g01_d2 g01_d3 g10 g10_d1 g10_d2 g10_d3 g11 g11_d1 g11_d2 g11_d3 t y0 y1 a0 a1 b bu th thu v0 v1
      = Gen.adj_f_s_general_22_ng_out_0_5 f0 f0_d1 f0_d2 f0_d3 f1 f1_d1 f1_d2 f1_d3 t y0 y1 a0 a1 b bu th thu ∧
    Gen.adj_fgp_s_general_22_ng_gp_0_0 f0 f0_d1 f0_d2 f0_d3 f1 f1_d1 f1_d2 f1_d3 g00 g00_d1 g00_d2 g00_d3 g01 g01_d1 g01_d2 g01_d3 g10 g10_d1 g10_d2 g10_d3 g11 g11_d1 g11_d2 g11_d3 t y0 y1 a0 a1 b bu th thu v0 v1
      = Gen.adj_gp_s_general_22_ng_out_0_0 g00 g00_d1 g00_d2 g00_d3 g01 g01_d1 g01_d2 g01_d3 g10 g10_d1 g10_d2 g10_d3 g11 g11_d1 g11_d2 g11_d3 t y0 y1 a0 a1 b bu th thu v0 v1 ∧
    Gen.adj_fgp_s_general_22_ng_gp_0_1 f0 f0_d1 f0_d2 f0_d3 f1 f1_d1 f1_d2 f1_d3 g00 g00_d1 g00_d2 g00_d3 g01 g01_d1 g01_d2 g01_d3 g10 g10_d1 g10_d2 g10_d3 g11 g11_d1 g11_d2 g11_d3 t y0 y1 a0 a1 b bu th thu v0 v1
      = Gen.adj_gp_s_general_22_ng_out_0_1 g00 g00_d1 g00_d2 g00_d3 g01 g01_d1 g01_d2 g01_d3 g10 g10_d1 g10_d2 g10_d3 g11 g11_d1 g11_d2 g11_d3 t y0 y1 a0 a1 b bu th thu v0 v1 ∧
    Gen.adj_fgp_s_general_22_ng_gp_0_2 f0 f0_d1 f0_d2 f0_d3 f1 f1_d1 f1_d2 f1_d3 g00 g00_d1 g00_d2 g00_d3 g01 g01_d1 g01_d2 g01_d3 g10 g10_d1 g10_d2 g10_d3 g11 g11_d1 g11_d2 g11_d3 t y0 y1 a0 a1 b bu th thu v0 v1
      = Gen.adj_gp_s_general_22_ng_out_0_2 g00 g00_d1 g00_d2 g00_d3 g01 g01_d1 g01_d2 g01_d3 g10 g10_d1 g10_d2 g10_d3 g11 g11_d1 g11_d2 g11_d3 t y0 y1 a0 a1 b bu th thu v0 v1 ∧
    Gen.adj_fgp_s_general_22_ng_gp_0_3 f0 f0_d1 f0_d2 f0_d3 f1 f1_d1 f1_d2 f1_d3 g00 g00_d1 g00_d2 g00_d3 g01 g01_d1 g01_d2 g01_d3 g10 g10_d1 g10_d2 g10_d3 g11 g11_d1 g11_d2 g11_d3 t y0 y1 a0 a1 b bu th thu v0 v1
      = Gen.adj_gp_s_general_22_ng_out_0_3 g00 g00_d1 g00_d2 g00_d3 g01 g01_d1 g01_d2 g01_d3 g10 g10_d1 g10_d2 g10_d3 g11 g11_d1 g11_d2 g11_d3 t y0 y1 a0 a1 b bu th thu v0 v1 ∧
    Gen.adj_fgp_s_general_22_ng_gp_0_4 f0 f0_d1 f0_d2 f0_d3 f1 f1_d1 f1_d2 f1_d3 g00 g00_d1 g00_d2 g00_d3 g01 g01_d1 g01_d2 g01_d3 g10 g10_d1 g10_d2 g10_d3 g11 g11_d1 g11_d2 g11_d3 t y0 y1 a0 a1 b bu th thu v0 v1
      = Gen.adj_gp_s_general_22_ng_out_0_4 g00 g00_d1 g00_d2 g00_d3 g01 g01_d1 g01_d2 g01_d3 g10 g10_d1 g10_d2 g10_d3 g11 g11_d1 g11_d2 g11_d3 t y0 y1 a0 a1 b bu th thu v0 v1 ∧
    Gen.adj_fgp_s_general_22_ng_gp_0_5 f0 f0_d1 f0_d2 f0_d3 f1 f1_d1 f1_d2 f1_d3 g00 g00_d1 g00_d2 g00_d3 g01 g01_d1 g01_d2 g01_d3 g10 g10_d1 g10_d2 g10_d3 g11 g11_d1 g11_d2 g11_d3 t y0 y1 a0 a1 b bu th thu v0 v1
      = Gen.adj_gp_s_general_22_ng_out_0_5 g00 g00_d1 g00_d2 g00_d3 g01 g01_d1 g01_d2 g01_d3 g10 g10_d1 g10_d2 g10_d3 g11 g11_d1 g11_d2 g11_d3 t y0 y1 a0 a1 b bu th thu v0 v1 := by
  refine ⟨?_, ?_, ?_, ?_, ?_, ?_, ?_, ?_, ?_, ?_, ?_, ?_⟩ <;> simp only [Gen.adj_fgp_s_general_22_ng_f_0_0, Gen.adj_f_s_general_22_ng_out_0_0, Gen.adj_fgp_s_general_22_ng_f_0_1, Gen.adj_f_s_general_22_ng_out_0_1, Gen.adj_fgp_s_general_22_ng_f_0_2, Gen.adj_f_s_general_22_ng_out_0_2, Gen.adj_fgp_s_general_22_ng_f_0_3, Gen.adj_f_s_general_22_ng_out_0_3, Gen.adj_fgp_s_general_22_ng_f_0_4, Gen.adj_f_s_general_22_ng_out_0_4, Gen.adj_fgp_s_general_22_ng_f_0_5, Gen.adj_f_s_general_22_ng_out_0_5, Gen.adj_fgp_s_general_22_ng_gp_0_0, Gen.adj_gp_s_general_22_ng_out_0_0, Gen.adj_fgp_s_general_22_ng_gp_0_1, Gen.adj_gp_s_general_22_ng_out_0_1, Gen.adj_fgp_s_general_22_ng_gp_0_2, Gen.adj_gp_s_general_22_ng_out_0_2, Gen.adj_fgp_s_general_22_ng_gp_0_3, Gen.adj_gp_s_general_22_ng_out_0_3, Gen.adj_fgp_s_general_22_ng_gp_0_4, Gen.adj_gp_s_general_22_ng_out_0_4, Gen.adj_fgp_s_general_22_ng_gp_0_5, Gen.adj_gp_s_general_22_ng_out_0_5] <;> ring

theorem adj_fgp_s_general_22_ng_graph (f0 : K → K → K → K → K) (f0_d1 : K → K → K → K → K) (f0_d2 : K → K → K → K → K) (f0_d3 : K → K → K → K → K) (f1 : K → K → K → K → K) (f1_d1 : K → K → K → K → K) (f1_d2 : K → K → K → K → K) (f1_d3 : K → K → K → K → K) (g00 : K → K → K → K → K) (g00_d1 : K → K → K → K → K) (g00_d11 : K → K → K → K → K) (g00_d12 : K → K → K → K → K) (g00_d13 : K → K → K → K → K) (g00_d2 : K → K → K → K → K) (g00_d22 : K → K → K → K → K) (g00_d23 : K → K → K → K → K) (g00_d3 : K → K → K → K → K) (g01 : K → K → K → K → K) (g01_d1 : K → K → K → K → K) (g01_d11 : K → K → K → K → K) (g01_d12 : K → K → K → K → K) (g01_d13 : K → K → K → K → K) (g01_d2 : K → K → K → K → K) (g01_d22 : K → K → K → K → K) (g01_d23 : K → K → K → K → K) (g01_d3 : K → K → K → K → K) (g10 : K → K → K → K → K) (g10_d1 : K → K → K → K → K) (g10_d11 : K → K → K → K → K) (g10_d12 : K → K → K → K → K) (g10_d13 : K → K → K → K → K) (g10_d2 : K → K → K → K → K) (g10_d22 : K → K → K → K → K) (g10_d23 : K → K → K → K → K) (g10_d3 : K → K → K → K → K) (g11 : K → K → K → K → K) (g11_d1 : K → K → K → K → K) (g11_d11 : K → K → K → K → K) (g11_d12 : K → K → K → K → K) (g11_d13 : K → K → K → K → K) (g11_d2 : K → K → K → K → K) (g11_d22 : K → K → K → K → K) (g11_d23 : K → K → K → K → K) (g11_d3 : K → K → K → K → K) (t y0 y1 a0 a1 b bu th thu v0 v1 : K) :
    Gen.adj_fgp_s_general_22_ng_rg_f f0 f0_d1 f0_d2 f0_d3 f1 f1_d1 f1_d2 f1_d3 g00 g00_d1 g00_d2 g00_d3 g01 g01_d1 g01_d2 g01_d3 g10 g10_d1 g10_d2 g10_d3 g11 g11_d1 g11_d2 g11_d3 t y0 y1 a0 a1 b bu th thu v0 v1 = 0 ∧
    Gen.adj_fgp_s_general_22_ng_leaf_f f0 f0_d1 f0_d2 f0_d3 f1 f1_d1 f1_d2 f1_d3 g00 g00_d1 g00_d2 g00_d3 g01 g01_d1 g01_d2 g01_d3 g10 g10_d1 g10_d2 g10_d3 g11 g11_d1 g11_d2 g11_d3 t y0 y1 a0 a1 b bu th thu v0 v1 = 1 ∧
    Gen.adj_fgp_s_general_22_ng_rg_gp f0 f0_d1 f0_d2 f0_d3 f1 f1_d1 f1_d2 f1_d3 g00 g00_d1 g00_d2 g00_d3 g01 g01_d1 g01_d2 g01_d3 g10 g10_d1 g10_d2 g10_d3 g11 g11_d1 g11_d2 g11_d3 t y0 y1 a0 a1 b bu th thu v0 v1 = 0 ∧
    Gen.adj_fgp_s_general_22_ng_leaf_gp f0 f0_d1 f0_d2 f0_d3 f1 f1_d1 f1_d2 f1_d3 g00 g00_d1 g00_d2 g00_d3 g01 g01_d1 g01_d2 g01_d3 g10 g10_d1 g10_d2 g10_d3 g11 g11_d1 g11_d2 g11_d3 t y0 y1 a0 a1 b bu th thu v0 v1 = 1 ∧
    Gen.adj_fgp_s_general_22_ng_rg_z_after f0 f0_d1 f0_d2 f0_d3 f1 f1_d1 f1_d2 f1_d3 g00 g00_d1 g00_d2 g00_d3 g01 g01_d1 g01_d2 g01_d3 g10 g10_d1 g10_d2 g10_d3 g11 g11_d1 g11_d2 g11_d3 t y0 y1 a0 a1 b bu th thu v0 v1 = 0 ∧
    Gen.adj_fgp_s_general_22_ng_leaf_z_after f0 f0_d1 f0_d2 f0_d3 f1 f1_d1 f1_d2 f1_d3 g00 g00_d1 g00_d2 g00_d3 g01 g01_d1 g01_d2 g01_d3 g10 g10_d1 g10_d2 g10_d3 g11 g11_d1 g11_d2 g11_d3 t y0 y1 a0 a1 b bu th thu v0 v1 = 1 := by
  refine ⟨?_, ?_, ?_, ?_, ?_, ?_⟩ <;> simp only [Gen.adj_fgp_s_general_22_ng_rg_f, Gen.adj_fgp_s_general_22_ng_leaf_f, Gen.adj_fgp_s_general_22_ng_rg_gp, Gen.adj_fgp_s_general_22_ng_leaf_gp, Gen.adj_fgp_s_general_22_ng_rg_z_after, Gen.adj_fgp_s_general_22_ng_leaf_z_after]

theorem adj_fgp_s_general_22_en_unused_param_zero (f0 : K → K → K → K → K) (f0_d1 : K → K → K → K → K) (f0_d2 : K → K → K → K → K) (f0_d3 : K → K → K → K → K) (f1 : K → K → K → K → K) (f1_d1 : K → K → K → K → K) (f1_d2 : K → K → K → K → K) (f1_d3 : K → K → K → K → K) (g00 : K → K → K → K → K) (g00_d1 : K → K → K → K → K) (g00_d11 : K → K → K → K → K) (g00_d12 : K → K → K → K → K) (g00_d13 : K → K → K → K → K) (g00_d2 : K → K → K → K → K) (g00_d22 : K → K → K → K → K) (g00_d23 : K → K → K → K → K) (g00_d3 : K → K → K → K → K) (g01 : K → K → K → K → K) (g01_d1 : K → K → K → K → K) (g01_d11 : K → K → K → K → K) (g01_d12 : K → K → K → K → K) (g01_d13 : K → K → K → K → K) (g01_d2 : K → K → K → K → K) (g01_d22 : K → K → K → K → K) (g01_d23 : K → K → K → K → K) (g01_d3 : K → K → K → K → K) (g10 : K → K → K → K → K) (g10_d1 : K → K → K → K → K) (g10_d11 : K → K → K → K → K) (g10_d12 : K → K → K → K → K) (g10_d13 : K → K → K → K → K) (g10_d2 : K → K → K → K → K) (g10_d22 : K → K → K → K → K) (g10_d23 : K → K → K → K → K) (g10_d3 : K → K → K → K → K) (g11 : K → K → K → K → K) (g11_d1 : K → K → K → K → K) (g11_d11 : K → K → K → K → K) (g11_d12 : K → K → K → K → K) (g11_d13 : K → K → K → K → K) (g11_d2 : K → K → K → K → K) (g11_d22 : K → K → K → K → K) (g11_d23 : K → K → K → K → K) (g11_d3 : K → K → K → K → K) (t y0 y1 a0 a1 b bu th thu v0 v1 : K) :
    Gen.adj_fgp_s_general_22_en_f_0_5 f0 f0_d1 f0_d2 f0_d3 f1 f1_d1 f1_d2 f1_d3 g00 g00_d1 g00_d2 g00_d3 g01 g01_d1 g01_d2 g01_d3 g10 g10_d1 g10_d2 g10_d3 g11 g11_d1 g11_d2 g11_d3 t y0 y1 a0 a1 b bu th thu v0 v1 = 0 ∧
    Gen.adj_fgp_s_general_22_en_gp_0_5 f0 f0_d1 f0_d2 f0_d3 f1 f1_d1 f1_d2 f1_d3 g00 g00_d1 g00_d2 g00_d3 g01 g01_d1 g01_d2 g01_d3 g10 g10_d1 g10_d2 g10_d3 g11 g11_d1 g11_d2 g11_d3 t y0 y1 a0 a1 b bu th thu v0 v1 = 0 := by
  refine ⟨?_, ?_⟩ <;> simp [Gen.adj_fgp_s_general_22_en_f_0_5, Gen.adj_fgp_s_general_22_en_gp_0_5]

theorem adj_fgp_s_general_22_en_pair (f0 : K → K → K → K → K) (f0_d1 : K → K → K → K → K) (f0_d2 : K → K → K → K → K) (f0_d3 : K → K → K → K → K) (f1 : K → K → K → K → K) (f1_d1 : K → K → K → K → K) (f1_d2 : K → K → K → K → K) (f1_d3 : K → K → K → K → K) (g00 : K → K → K → K → K) (g00_d1 : K → K → K → K → K) (g00_d11 : K → K → K → K → K) (g00_d12 : K → K → K → K → K) (g00_d13 : K → K → K → K → K) (g00_d2 : K → K → K → K → K) (g00_d22 : K → K → K → K → K) (g00_d23 : K → K → K → K → K) (g00_d3 : K → K → K → K → K) (g01 : K → K → K → K → K) (g01_d1 : K → K → K → K → K) (g01_d11 : K → K → K → K → K) (g01_d12 : K → K → K → K → K) (g01_d13 : K → K → K → K → K) (g01_d2 : K → K → K → K → K) (g01_d22 : K → K → K → K → K) (g01_d23 : K → K → K → K → K) (g01_d3 : K → K → K → K → K) (g10 : K → K → K → K → K) (g10_d1 : K → K → K → K → K) (g10_d11 : K → K → K → K → K) (g10_d12 : K → K → K → K → K) (g10_d13 : K → K → K → K → K) (g10_d2 : K → K → K → K → K) (g10_d22 : K → K → K → K → K) (g10_d23 : K → K → K → K → K) (g10_d3 : K → K → K → K → K) (g11 : K → K → K → K → K) (g11_d1 : K → K → K → K → K) (g11_d11 : K → K → K → K → K) (g11_d12 : K → K → K → K → K) (g11_d13 : K → K → K → K → K) (g11_d2 : K → K → K → K → K) (g11_d22 : K → K → K → K → K) (g11_d23 : K → K → K → K → K) (g11_d3 : K → K → K → K → K) (t y0 y1 a0 a1 b bu th thu v0 v1 : K) :
    Gen.adj_fgp_s_general_22_en_f_0_0 f0 f0_d1 f0_d2 f0_d3 f1 f1_d1 f1_d2 f1_d3 g00 g00_d1 g00_d2 g00_d3 g01 g01_d1 g01_d2 g01_d3 g10 g10_d1 g10_d2 g10_d3 g11 g11_d1 g11_d2 g11_d3 t y0 y1 a0 a1 b bu th thu v0 v1
      = Gen.adj_f_s_general_22_en_out_0_0 f0 f0_d1 f0_d2 f0_d3 f1 f1_d1 f1_d2 f1_d3 t y0 y1 a0 a1 b bu th thu ∧
    Gen.adj_fgp_s_general_22_en_f_0_1 f0 f0_d1 f0_d2 f0_d3 f1 f1_d1 f1_d2 f1_d3 g00 g00_d1 g00_d2 g00_d3 g01 g01_d1 g01_d2 g01_d3 g10 g10_d1 g10_d2 g10_d3 g11 g11_d1 g11_d2 g11_d3 t y0 y1 a0 a1 b bu th thu v0 v1
      = Gen.adj_f_s_general_22_en_out_0_1 f0 f0_d1 f0_d2 f0_d3 f1 f1_d1 f1_d2 f1_d3 t y0 y1 a0 a1 b bu th thu ∧
    Gen.adj_fgp_s_general_22_en_f_0_2 f0 f0_d1 f0_d2 f0_d3 f1 f1_d1 f1_d2 f1_d3 g00 g00_d1 g00_d2 g00_d3 g01 g01_d1 g01_d2 g01_d3 g10 g10_d1 g10_d2 g10_d3 g11 g11_d1 g11_d2 g11_d3 t y0 y1 a0 a1 b bu th thu v0 v1
      = Gen.adj_f_s_general_22_en_out_0_2 f0 f0_d1 f0_d2 f0_d3 f1 f1_d1 f1_d2 f1_d3 t y0 y1 a0 a1 b bu th thu ∧
    Gen.adj_fgp_s_general_22_en_f_0_3 f0 f0_d1 f0_d2 f0_d3 f1 f1_d1 f1_d2 f1_d3 g00 g00_d1 g00_d2 g00_d3 g01 g01_d1 g01_d2 g01_d3 g10 g10_d1 g10_d2 g10_d3 g11 g11_d1 g11_d2 g11_d3 t y0 y1 a0 a1 b bu th thu v0 v1
      = Gen.adj_f_s_general_22_en_out_0_3 f0 f0_d1 f0_d2 f0_d3 f1 f1_d1 f1_d2 f1_d3 t y0 y1 a0 a1 b bu th thu ∧
    Gen.adj_fgp_s_general_22_en_f_0_4 f0 f0_d1 f0_d2 f0_d3 f1 f1_d1 f1_d2 f1_d3 g00 g00_d1 g00_d2 g00_d3 g01 g01_d1 g01_d2 g01_d3 g10 g10_d1 g10_d2 g10_d3 g11 g11_d1 g11_d2 g11_d3 t y0 y1 a0 a1 b bu th thu v0 v1
      = Gen.adj_f_s_general_22_en_out_0_4 f0 f0_d1 f0_d2 f0_d3 f1 f1_d1 f1_d2 f1_d3 t y0 y1 a0 a1 b bu th thu ∧
    Gen.adj_fgp_s_general_22_en_f_0_5 f0 f0_d1 f0_d2 f0_d3 f1 f1_d1 f1_d2 f1_d3 g00 g00_d1 g00_d2 g00_d3 g01 g01_d1 g01_d2 g01_d3 g10 g10_d1 g10_d2 g10_d3 g11 g11_d1 g11_d2 g11_d3 t y0 y1 a0 a1 b bu th thu v0 v1
      = Gen.adj_f_s_general_22_en_out_0_5 f0 f0_d1 f0_d2 f0_d3 f1 f1_d1 f1_d2 f1_d3 t y0 y1 a0 a1 b bu th thu ∧
    Gen.adj_fgp_s_general_22_en_gp_0_0 f0 f0_d1 f0_d2 f0_d3 f1 f1_d1 f1_d2 f1_d3 g00 g00_d1 g00_d2 g00_d3 g01 g01_d1 g01_d2 g01_d3 g10 g10_d1 g10_d2 g10_d3 g11 g11_d1 g11_d2 g11_d3 t y0 y1 a0 a1 b bu th thu v0 v1
      = Gen.adj_gp_s_general_22_en_out_0_0 g00 g00_d1 g00_d2 g00_d3 g01 g01_d1 g01_d2 g01_d3 g10 g10_d1 g10_d2 g10_d3 g11 g11_d1 g11_d2 g11_d3 t y0 y1 a0 a1 b bu th thu v0 v1 ∧
    Gen.adj_fgp_s_general_22_en_gp_0_1 f0 f0_d1 f0_d2 f0_d3 f1 f1_d1 f1_d2 f1_d3 g00 g00_d1 g00_d2 g00_d3 g01 g01_d1 g01_d2 g01_d3 g10 g10_d1 g10_d2 g10_d3 g11 g11_d1 g11_d2 g11_d3 t y0 y1 a0 a1 b bu th thu v0 v1
      = Gen.adj_gp_s_general_22_en_out_0_1 g00 g00_d1 g00_d2 g00_d3 g01 g01_d1 g01_d2 g01_d3 g10 g10_d1 g10_d2 g10_d3 g11 g11_d1 g11_d2 g11_d3 t y0 y1 a0 a1 b bu th thu v0 v1 ∧
    Gen.adj_fgp_s_general_22_en_gp_0_2 f0 f0_d1 f0_d2 f0_d3 f1 f1_d1 f1_d2 f1_d3 g00 g00_d1 g00_d2 g00_d3 g01 g01_d1 g01_d2 g01_d3 g10 g10_d1 g10_d2 g10_d3 g11 g11_d1 g11_d2 g11_d3 t y0 y1 a0 a1 b bu th thu v0 v1
      = Gen.adj_gp_s_general_22_en_out_0_2 g00 g00_d1 g00_d2 g00_d3 g01 g01_d1 g01_d2 g01_d3 g10 g10_d1 g10_d2 g10_d3 g11 g11_d1 g11_d2 g11_d3 t y0 y1 a0 a1 b bu th thu v0 v1 ∧
    Gen.adj_fgp_s_general_22_en_gp_0_3 f0 f0_d1 f0_d2 f0_d3 f1 f1_d1 f1_d2 f1_d3 g00 g00_d1 g00_d2 g00_d3 g01 g01_d1 g01_d2 g01_d3 g10 g10_d1 g10_d2 g10_d3 g11 g11_d1 g11_d2 g11_d3 t y0 y1 a0 a1 b bu th thu v0 v1
      = Gen.adj_gp_s_general_22_en_out_0_3 g00 g00_d1 g00_d2 g00_d3 g01 g01_d1 g01_d2 g01_d3 g10 g10_d1 g10_d2 g10_d3 g11 g11_d1 g11_d2 g11_d3 t y0 y1 a0 a1 b bu th thu v0 v1 ∧
    Gen.adj_fgp_s_general_22_en_gp_0_4 f0 f0_d1 f0_d2 f0_d3 f1 f1_d1 f1_d2 f1_d3 g00 g00_d1 g00_d2 g00_d3 g01 g01_d1 g01_d2 g01_d3 g10 g10_d1 g10_d2 g10_d3 g11 g11_d1 g11_d2 g11_d3 t y0 y1 a0 a1 b bu th thu v0 v1
      = Gen.adj_gp_s_general_22_en_out_0_4 g00 g00_d1 g00_d2 g00_d3 g01 g01_d1 g01_d2 g01_d3 g10 g10_d1 g10_d2 g10_d3 g11 g11_d1 g11_d2 g11_d3 t y0 y1 a0 a1 b bu th thu v0 v1 ∧
    Gen.adj_fgp_s_general_22_en_gp_0_5 f0 f0_d1 f0_d2 f0_d3 f1 f1_d1 f1_d2 f1_d3 g00 g00_d1 g00_d2 g00_d3 g01 g01_d1 g01_d2 g01_d3 g10 g10_d1 g10_d2 g10_d3 g11 g11_d1 g11_d2 g11_d3 t y0 y1 a0 a1 b bu th thu v0 v1
      = Gen.adj_gp_s_general_22_en_out_0_5 g00 g00_d1 g00_d2 g00_d3 g01 g01_d1 g01_d2 g01_d3 g10 g10_d1 g10_d2 g10_d3 g11 g11_d1 g11_d2 g11_d3 t y0 y1 a0 a1 b bu th thu v0 v1 := by
  refine ⟨?_, ?_, ?_, ?_, ?_, ?_, ?_, ?_, ?_, ?_, ?_, ?_⟩ <;> simp only [Gen.adj_fgp_s_general_22_en_f_0_0, Gen.adj_f_s_general_22_en_out_0_0, Gen.adj_fgp_s_general_22_en_f_0_1, Gen.adj_f_s_general_22_en_out_0_1, Gen.adj_fgp_s_general_22_en_f_0_2, Gen.adj_f_s_general_22_en_out_0_2, Gen.adj_fgp_s_general_22_en_f_0_3, Gen.adj_f_s_general_22_en_out_0_3, Gen.adj_fgp_s_general_22_en_f_0_4, Gen.adj_f_s_general_22_en_out_0_4, Gen.adj_fgp_s_general_22_en_f_0_5, Gen.adj_f_s_general_22_en_out_0_5, Gen.adj_fgp_s_general_22_en_gp_0_0, Gen.adj_gp_s_general_22_en_out_0_0, Gen.adj_fgp_s_general_22_en_gp_0_1, Gen.adj_gp_s_general_22_en_out_0_1, Gen.adj_fgp_s_general_22_en_gp_0_2, Gen.adj_gp_s_general_22_en_out_0_2, Gen.adj_fgp_s_general_22_en_gp_0_3, Gen.adj_gp_s_general_22_en_out_0_3, Gen.adj_fgp_s_general_22_en_gp_0_4, Gen.adj_gp_s_general_22_en_out_0_4, Gen.adj_fgp_s_general_22_en_gp_0_5, Gen.adj_gp_s_general_22_en_out_0_5] <;> ring

theorem adj_fgp_s_general_22_en_graph (f0 : K → K → K → K → K) (f0_d1 : K → K → K → K → K) (f0_d2 : K → K → K → K → K) (f0_d3 : K → K → K → K → K) (f1 : K → K → K → K → K) (f1_d1 : K → K → K → K → K) (f1_d2 : K → K → K → K → K) (f1_d3 : K → K → K → K → K) (g00 : K → K → K → K → K) (g00_d1 : K → K → K → K → K) (g00_d11 : K → K → K → K → K) (g00_d12 : K → K → K → K → K) (g00_d13 : K → K → K → K → K) (g00_d2 : K → K → K → K → K) (g00_d22 : K → K → K → K → K) (g00_d23 : K → K → K → K → K) (g00_d3 : K → K → K → K → K) (g01 : K → K → K → K → K) (g01_d1 : K → K → K → K → K) (g01_d11 : K → K → K → K → K) (g01_d12 : K → K → K → K → K) (g01_d13 : K → K → K → K → K) (g01_d2 : K → K → K → K → K) (g01_d22 : K → K → K → K → K) (g01_d23 : K → K → K → K → K) (g01_d3 : K → K → K → K → K) (g10 : K → K → K → K → K) (g10_d1 : K → K → K → K → K) (g10_d11 : K → K → K → K → K) (g10_d12 : K → K → K → K → K) (g10_d13 : K → K → K → K → K) (g10_d2 : K → K → K → K → K) (g10_d22 : K → K → K → K → K) (g10_d23 : K → K → K → K → K) (g10_d3 : K → K → K → K → K) (g11 : K → K → K → K → K) (g11_d1 : K → K → K → K → K) (g11_d11 : K → K → K → K → K) (g11_d12 : K → K → K → K → K) (g11_d13 : K → K → K → K → K) (g11_d2 : K → K → K → K → K) (g11_d22 : K → K → K → K → K) (g11_d23 : K → K → K → K → K) (g11_d3 : K → K → K → K → K) (t y0 y1 a0 a1 b bu th thu v0 v1 : K) :
    Gen.adj_fgp_s_general_22_en_rg_f f0 f0_d1 f0_d2 f0_d3 f1 f1_d1 f1_d2 f1_d3 g00 g00_d1 g00_d2 g00_d3 g01 g01_d1 g01_d2 g01_d3 g10 g10_d1 g10_d2 g10_d3 g11 g11_d1 g11_d2 g11_d3 t y0 y1 a0 a1 b bu th thu v0 v1 = 1 ∧
    Gen.adj_fgp_s_general_22_en_leaf_f f0 f0_d1 f0_d2 f0_d3 f1 f1_d1 f1_d2 f1_d3 g00 g00_d1 g00_d2 g00_d3 g01 g01_d1 g01_d2 g01_d3 g10 g10_d1 g10_d2 g10_d3 g11 g11_d1 g11_d2 g11_d3 t y0 y1 a0 a1 b bu th thu v0 v1 = 0 ∧
    Gen.adj_fgp_s_general_22_en_rg_gp f0 f0_d1 f0_d2 f0_d3 f1 f1_d1 f1_d2 f1_d3 g00 g00_d1 g00_d2 g00_d3 g01 g01_d1 g01_d2 g01_d3 g10 g10_d1 g10_d2 g10_d3 g11 g11_d1 g11_d2 g11_d3 t y0 y1 a0 a1 b bu th thu v0 v1 = 1 ∧
    Gen.adj_fgp_s_general_22_en_leaf_gp f0 f0_d1 f0_d2 f0_d3 f1 f1_d1 f1_d2 f1_d3 g00 g00_d1 g00_d2 g00_d3 g01 g01_d1 g01_d2 g01_d3 g10 g10_d1 g10_d2 g10_d3 g11 g11_d1 g11_d2 g11_d3 t y0 y1 a0 a1 b bu th thu v0 v1 = 0 ∧
    Gen.adj_fgp_s_general_22_en_rg_z_after f0 f0_d1 f0_d2 f0_d3 f1 f1_d1 f1_d2 f1_d3 g00 g00_d1 g00_d2 g00_d3 g01 g01_d1 g01_d2 g01_d3 g10 g10_d1 g10_d2 g10_d3 g11 g11_d1 g11_d2 g11_d3 t y0 y1 a0 a1 b bu th thu v0 v1 = 1 ∧
    Gen.adj_fgp_s_general_22_en_leaf_z_after f0 f0_d1 f0_d2 f0_d3 f1 f1_d1 f1_d2 f1_d3 g00 g00_d1 g00_d2 g00_d3 g01 g01_d1 g01_d2 g01_d3 g10 g10_d1 g10_d2 g10_d3 g11 g11_d1 g11_d2 g11_d3 t y0 y1 a0 a1 b bu th thu v0 v1 = 1 := by
  refine ⟨?_, ?_, ?_, ?_, ?_, ?_⟩ <;> simp only [Gen.adj_fgp_s_general_22_en_rg_f, Gen.adj_fgp_s_general_22_en_leaf_f, Gen.adj_fgp_s_general_22_en_rg_gp, Gen.adj_fgp_s_general_22_en_leaf_gp, Gen.adj_fgp_s_general_22_en_rg_z_after, Gen.adj_fgp_s_general_22_en_leaf_z_after]

end C11
