/-
C15 — reversible Heun is algebraically reversible.

`F` is the regenerated `ReversibleHeun.step` (scalar / diagonal d = 1 and general noise d = m = 2, traced from the real
class).  The reverse pass is THE SAME generated step applied to the time-reversed, negated SDE
`f'(t,y) = -f(-t,y)`, `g'(t,y) = -g(-t,y)` on `[-t1,-t0]`, fed the same increment (that is what
`ReverseBrownian` returns for `(-t1,-t0)`, see `C03.reverse_chen`) and the negated extra state `(-f1,-g1,z1)` —
exactly the construction of tests/test_sdeint.py::test_reversibility.  `f`, `g` are arbitrary functions.
-/
import Tsv.Gen.Steps
import Mathlib.Tactic.Ring
import Mathlib.Tactic.FieldSimp
import Mathlib.Algebra.CharZero.Defs

namespace C15
variable {K : Type} [Field K] [LinearOrder K] [CharZero K]
set_option linter.unusedSectionVars false

section scalar
variable (f g : K → K → K) (t0 t1 y0 dW z0 f0 g0 : K)

local notation "Y1" => Gen.reversible_heun_s_diagonal_11_y1_0_0 f g t0 t1 y0 dW z0 f0 g0
local notation "Z1" => Gen.reversible_heun_s_diagonal_11_z1_0_0 f g t0 t1 y0 dW z0 f0 g0
local notation "F1" => Gen.reversible_heun_s_diagonal_11_f1_0_0 f g t0 t1 y0 dW z0 f0 g0
local notation "G1" => Gen.reversible_heun_s_diagonal_11_g1_0_0 f g t0 t1 y0 dW z0 f0 g0

/-- the negated, time-reversed SDE -/
def neg (h : K → K → K) : K → K → K := fun t y => - h (-t) y

/-- structural invariant: the new extra state is the vector field at the new `z`. -/
theorem rh_invariant_preserved :
    F1 = f t1 Z1 ∧ G1 = g t1 Z1 := by
  constructor <;> simp only [Gen.reversible_heun_s_diagonal_11_f1_0_0, Gen.reversible_heun_s_diagonal_11_g1_0_0,
    Gen.reversible_heun_s_diagonal_11_z1_0_0]

/-- the reverse step reconstructs `z0` (no hypothesis at all). -/
theorem rh_inverse_z :
    Gen.reversible_heun_s_diagonal_11_z1_0_0 (neg f) (neg g) (-t1) (-t0) Y1 dW Z1 (-F1) (-G1) = z0 := by
  simp only [Gen.reversible_heun_s_diagonal_11_z1_0_0, Gen.reversible_heun_s_diagonal_11_y1_0_0,
    Gen.reversible_heun_s_diagonal_11_f1_0_0, Gen.reversible_heun_s_diagonal_11_g1_0_0]
  field_simp
  ring

/-- the reverse step is the exact inverse of the forward step on states satisfying the invariant
`f0 = f t0 z0`, `g0 = g t0 z0`: it returns `(y0, z0, -f0, -g0)`. -/
theorem rh_inverse (hf : f0 = f t0 z0) (hg : g0 = g t0 z0) :
    Gen.reversible_heun_s_diagonal_11_y1_0_0 (neg f) (neg g) (-t1) (-t0) Y1 dW Z1 (-F1) (-G1) = y0 ∧
    Gen.reversible_heun_s_diagonal_11_z1_0_0 (neg f) (neg g) (-t1) (-t0) Y1 dW Z1 (-F1) (-G1) = z0 ∧
    Gen.reversible_heun_s_diagonal_11_f1_0_0 (neg f) (neg g) (-t1) (-t0) Y1 dW Z1 (-F1) (-G1) = -f0 ∧
    Gen.reversible_heun_s_diagonal_11_g1_0_0 (neg f) (neg g) (-t1) (-t0) Y1 dW Z1 (-F1) (-G1) = -g0 := by
  have hz := rh_inverse_z f g t0 t1 y0 dW z0 f0 g0
  have inv := rh_invariant_preserved (neg f) (neg g) (-t1) (-t0) Y1 dW Z1 (-F1) (-G1)
  have hF : Gen.reversible_heun_s_diagonal_11_f1_0_0 (neg f) (neg g) (-t1) (-t0) Y1 dW Z1 (-F1) (-G1) = -f0 := by
    rw [inv.1, hz, hf]; simp [neg]
  have hG : Gen.reversible_heun_s_diagonal_11_g1_0_0 (neg f) (neg g) (-t1) (-t0) Y1 dW Z1 (-F1) (-G1) = -g0 := by
    rw [inv.2, hz, hg]; simp [neg]
  refine ⟨?_, hz, hF, hG⟩
  -- y: express the reverse y-update through the reverse f1,g1 just computed
  have key : Gen.reversible_heun_s_diagonal_11_y1_0_0 (neg f) (neg g) (-t1) (-t0) Y1 dW Z1 (-F1) (-G1)
      = Y1 + ((-F1) + Gen.reversible_heun_s_diagonal_11_f1_0_0 (neg f) (neg g) (-t1) (-t0) Y1 dW Z1 (-F1) (-G1))
          * ((1/2) * (-t0 - -t1))
        + ((-G1) + Gen.reversible_heun_s_diagonal_11_g1_0_0 (neg f) (neg g) (-t1) (-t0) Y1 dW Z1 (-F1) (-G1))
          * ((1/2) * dW) := by
    simp only [Gen.reversible_heun_s_diagonal_11_y1_0_0, Gen.reversible_heun_s_diagonal_11_f1_0_0,
      Gen.reversible_heun_s_diagonal_11_g1_0_0]
  rw [key, hF, hG]
  simp only [Gen.reversible_heun_s_diagonal_11_y1_0_0, Gen.reversible_heun_s_diagonal_11_f1_0_0,
    Gen.reversible_heun_s_diagonal_11_g1_0_0]
  field_simp
  ring

end scalar

/-! ### Any number of steps

The trajectory statement is a generic fact about invertible steps; it is instantiated with the scalar step. -/

section trajectory
variable {S I : Type} (Fw Bw : I → S → S) (Inv : S → Prop)

/-- run the forward steps in order -/
def runF : List I → S → S
  | [], s => s
  | i :: is, s => runF is (Fw i s)

/-- run the reverse steps in the opposite order -/
def runB : List I → S → S
  | [], s => s
  | i :: is, s => Bw i (runB is s)

/-- if every reverse step undoes the corresponding forward step on invariant states and the invariant is
preserved, then the reverse run undoes the forward run — for every number of steps. -/
theorem run_reconstructs (hinv : ∀ i s, Inv s → Inv (Fw i s)) (hback : ∀ i s, Inv s → Bw i (Fw i s) = s) :
    ∀ (is : List I) (s : S), Inv s → runB Bw is (runF Fw is s) = s
  | [], s, _ => rfl
  | i :: is, s, h => by
      simp only [runF, runB]
      rw [run_reconstructs hinv hback is (Fw i s) (hinv i s h), hback i s h]

/-- every intermediate forward state is reproduced as well. -/
theorem run_reconstructs_prefix (hinv : ∀ i s, Inv s → Inv (Fw i s)) (hback : ∀ i s, Inv s → Bw i (Fw i s) = s)
    (pre post : List I) (s : S) (h : Inv s) :
    runB Bw post (runF Fw (pre ++ post) s) = runF Fw pre s := by
  induction pre generalizing s with
  | nil => simpa [runF] using run_reconstructs Fw Bw Inv hinv hback post s h
  | cons i is ih => simpa [runF] using ih (Fw i s) (hinv i s h)

end trajectory

section scalar_trajectory
variable (f g : K → K → K)

/-- solver state `(y, z, f, g)`; one step input `(t0, t1, dW)` -/
abbrev St (K : Type) := K × K × K × K
abbrev In (K : Type) := K × K × K

def stepF (i : In K) (s : St K) : St K :=
  (Gen.reversible_heun_s_diagonal_11_y1_0_0 f g i.1 i.2.1 s.1 i.2.2 s.2.1 s.2.2.1 s.2.2.2,
   Gen.reversible_heun_s_diagonal_11_z1_0_0 f g i.1 i.2.1 s.1 i.2.2 s.2.1 s.2.2.1 s.2.2.2,
   Gen.reversible_heun_s_diagonal_11_f1_0_0 f g i.1 i.2.1 s.1 i.2.2 s.2.1 s.2.2.1 s.2.2.2,
   Gen.reversible_heun_s_diagonal_11_g1_0_0 f g i.1 i.2.1 s.1 i.2.2 s.2.1 s.2.2.1 s.2.2.2)

/-- the backward step: negate the extra state, run the SAME generated step on the negated SDE over `[-t1,-t0]`,
negate the extra state back. -/
def stepB (i : In K) (s : St K) : St K :=
  let y := Gen.reversible_heun_s_diagonal_11_y1_0_0 (neg f) (neg g) (-i.2.1) (-i.1) s.1 i.2.2 s.2.1 (-s.2.2.1) (-s.2.2.2)
  let z := Gen.reversible_heun_s_diagonal_11_z1_0_0 (neg f) (neg g) (-i.2.1) (-i.1) s.1 i.2.2 s.2.1 (-s.2.2.1) (-s.2.2.2)
  let f' := Gen.reversible_heun_s_diagonal_11_f1_0_0 (neg f) (neg g) (-i.2.1) (-i.1) s.1 i.2.2 s.2.1 (-s.2.2.1) (-s.2.2.2)
  let g' := Gen.reversible_heun_s_diagonal_11_g1_0_0 (neg f) (neg g) (-i.2.1) (-i.1) s.1 i.2.2 s.2.1 (-s.2.2.1) (-s.2.2.2)
  (y, z, -f', -g')

/-- invariant of a state *entering* a step that starts at time `t`: extra state = vector field at `z`.
(The time is carried by the step inputs; consecutive steps share end points.) -/
def Consistent (t : K) (s : St K) : Prop := s.2.2.1 = f t s.2.1 ∧ s.2.2.2 = g t s.2.1

theorem stepB_stepF (i : In K) (s : St K) (h : Consistent f g i.1 s) : stepB f g i (stepF f g i s) = s := by
  obtain ⟨y, z, f0, g0⟩ := s
  obtain ⟨hf, hg⟩ := h
  have := rh_inverse f g i.1 i.2.1 y i.2.2 z f0 g0 hf hg
  simp only [stepB, stepF]
  obtain ⟨h1, h2, h3, h4⟩ := this
  simp only [h1, h2, h3, h4, neg_neg]

theorem stepF_consistent (i : In K) (s : St K) : Consistent f g i.2.1 (stepF f g i s) := by
  obtain ⟨y, z, f0, g0⟩ := s
  exact rh_invariant_preserved f g i.1 i.2.1 y i.2.2 z f0 g0

/-- a grid: consecutive steps share end points, starting at `t` -/
def Grid : K → List (In K) → Prop
  | _, [] => True
  | t, i :: is => i.1 = t ∧ Grid i.2.1 is

/-- the whole trajectory is reconstructed: for every number of steps on any grid and any increments. -/
theorem rh_trajectory_reconstructed : ∀ (is : List (In K)) (t : K) (s : St K), Grid t is → Consistent f g t s →
    runB (stepB f g) is (runF (stepF f g) is s) = s
  | [], _, _, _, _ => rfl
  | i :: is, t, s, hgrid, hc => by
      obtain ⟨ht, hrest⟩ := hgrid
      simp only [runF, runB]
      rw [rh_trajectory_reconstructed is i.2.1 (stepF f g i s) hrest (stepF_consistent f g i s)]
      exact stepB_stepF f g i s (ht ▸ hc)

/-- non-vacuity: the initial state `init_extra_solver_state` produces, `(y0, y0, f t0 y0, g t0 y0)`, is consistent. -/
example (t0 y0 : K) : Consistent f g t0 (y0, y0, f t0 y0, g t0 y0) := ⟨rfl, rfl⟩

end scalar_trajectory
end C15
