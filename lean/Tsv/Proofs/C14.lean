/-
C14 — adaptive stepping: accepted steps tile the interval, trial lengths respect dt_min, the accept/reject rule,
the returned values, and the controller's step-size factor bounds.

Model: the adaptive part of `Model/Loop.lean` (tied to the real `integrate` by vlib/corr_loop.py, which compares every
trial bit for bit); the controller `update_step_size` is REGENERATED (`Gen.usz_*`, four paths with their traced
branch conditions `pc0`, `pc1`).  The error estimate `err` is an ARBITRARY function, so every schedule the controller
can produce for any SDE / tolerance / Brownian path is covered.
Termination is proved in `C14Term.lean` (Archimedean ordered field, `dt_min > 0`, any error oracle); "tightening the tolerances
reduces the true error" is analytic and not proved (see DESIGN §4 C14).
-/
import Tsv.Model.Loop
import Tsv.Gen.Loop
import Tsv.Proofs.LoopCore
import Mathlib.Tactic.Ring
import Mathlib.Tactic.Linarith
import Mathlib.Tactic.Positivity
import Mathlib.Algebra.Order.Field.Basic

namespace C14
open Model.Loop LoopCore

section controller
variable {K : Type} [Field K] [LinearOrder K] [IsStrictOrderedRing K] (pw : K → K → K)

/-- the hand-written branch `if e > 1` of the model's controller is the branch the real code takes:
the traced path conditions of the four regenerated paths. -/
theorem usz_branch_tie (e h p : K) :
    (Gen.usz_rej_none_pc0 pw e h ↔ e > 1) ∧ (Gen.usz_rej_prev_pc0 pw e h p ↔ e > 1) ∧
    (Gen.usz_acc_none_pc0 pw e h ↔ e > 1) ∧ (Gen.usz_acc_prev_pc0 pw e h p ↔ e > 1) ∧
    (Gen.usz_acc_none_pc1 pw e h ↔ e ≤ 1) ∧ (Gen.usz_acc_prev_pc1 pw e h p ↔ e ≤ 1) := by
  simp only [Gen.usz_rej_none_pc0, Gen.usz_rej_prev_pc0, Gen.usz_acc_none_pc0, Gen.usz_acc_prev_pc0,
    Gen.usz_acc_none_pc1, Gen.usz_acc_prev_pc1, and_self, iff_self]

/-- rejected trial (`e > 1`): the new step size is between `0.2 h` and `h · max(0.2, pw(0.9/e, 2/3))`. -/
theorem factor_bounds_reject (e h p : K) (hh : 0 ≤ h) :
    (1 / 5) * h ≤ Gen.usz_rej_none_h pw e h ∧ Gen.usz_rej_none_h pw e h ≤ (7 / 5) * h ∧
    Gen.usz_rej_none_h pw e h ≤ h * max (1 / 5) (pw (9 / 10 / e) (2 / 3)) ∧
    (1 / 5) * h ≤ Gen.usz_rej_prev_h pw e h p ∧ Gen.usz_rej_prev_h pw e h p ≤ (7 / 5) * h ∧
    Gen.usz_rej_prev_h pw e h p ≤ h * max (1 / 5) (pw (9 / 10 / e) (2 / 3)) := by
  simp only [Gen.usz_rej_none_h, Gen.usz_rej_prev_h, pow_zero, mul_one]
  refine ⟨?_, ?_, ?_, ?_, ?_, ?_⟩
  all_goals first
    | (rw [mul_comm]; exact mul_le_mul_of_nonneg_left (le_min (by norm_num) (le_max_left _ _)) hh)
    | (rw [mul_comm ((7:K)/5)]; exact mul_le_mul_of_nonneg_left (min_le_left _ _) hh)
    | exact mul_le_mul_of_nonneg_left (min_le_right _ _) hh

/-- hence, whenever `pw x a < 1` for `0 < x < 1` (true of the real power function), a rejected trial strictly
shrinks the step: `new_h < h`. -/
theorem reject_shrinks (e h : K) (hh : 0 < h) (he : 1 < e) (hpw : pw (9 / 10 / e) (2 / 3) < 1) :
    Gen.usz_rej_none_h pw e h < h := by
  have := (factor_bounds_reject pw e h 0 (le_of_lt hh)).2.2.1
  have hm : max (1 / 5 : K) (pw (9 / 10 / e) (2 / 3)) < 1 := max_lt (by norm_num) hpw
  calc Gen.usz_rej_none_h pw e h ≤ h * max (1 / 5) (pw (9 / 10 / e) (2 / 3)) := this
    _ < h * 1 := mul_lt_mul_of_pos_left hm hh
    _ = h := mul_one h

/-- accepted trial (`e ≤ 1`): the step never shrinks and grows by at most 1.4. -/
theorem factor_bounds_accept (e h p : K) (hh : 0 ≤ h) :
    h ≤ Gen.usz_acc_none_h pw e h ∧ Gen.usz_acc_none_h pw e h ≤ (7 / 5) * h ∧
    h ≤ Gen.usz_acc_prev_h pw e h p ∧ Gen.usz_acc_prev_h pw e h p ≤ (7 / 5) * h := by
  simp only [Gen.usz_acc_none_h, Gen.usz_acc_prev_h]
  refine ⟨?_, ?_, ?_, ?_⟩
  all_goals first
    | (conv_lhs => rw [← mul_one h]
       exact mul_le_mul_of_nonneg_left (le_min (by norm_num) (le_max_left _ _)) hh)
    | (rw [mul_comm ((7:K)/5)]; exact mul_le_mul_of_nonneg_left (min_le_left _ _) hh)

end controller

/-! ### the adaptive loop -/
section loop
variable {T Y X : Type} [LinearOrder T]
variable (tEnd : T) (step : T → T → Y → X → Y × X)
variable (add : T → T → T) (half : T → T → T) (err : Y → Y → T) (update : T → T → Option T → Ctl T) (dtMin one : T)

local notation "AITER" => aiter tEnd step add half err update dtMin one

/-- after every controller update the step size is at least `dt_min` -/
theorem h_ge_dtmin (a : ASt T Y X) : dtMin ≤ (AITER a).1.h := by
  simp only [aiter]
  split <;> rename_i h
  · exact le_rfl
  · exact not_lt.mp h

/-- **Accept/reject rule.** A trial is rejected iff its error estimate exceeds 1 and the newly proposed step size is
still above `dt_min` (i.e. "unless the controller has reached dt_min"). -/
theorem reject_rule (a : ASt T Y X) :
    let nt := pmin (add a.s.ct a.h) tEnd
    let e := err (step a.s.ct nt a.s.cy a.s.cx).1
      (step (half a.s.ct nt) nt (step a.s.ct (half a.s.ct nt) a.s.cy a.s.cx).1
        (step a.s.ct (half a.s.ct nt) a.s.cy a.s.cx).2).1
    (AITER a).2.1 = false ↔ (one < e ∧ dtMin < (AITER a).1.h) := by
  simp only [aiter]
  split <;> rename_i h <;> simp [not_le]

/-- a rejected trial leaves `(curr_t, curr_y, extra)` untouched; an accepted one moves to `next_t` with the
TWO-HALF-STEP value and extra state (never the full-step value). -/
theorem trial_effect (a : ASt T Y X) :
    let nt := pmin (add a.s.ct a.h) tEnd
    let m := step a.s.ct (half a.s.ct nt) a.s.cy a.s.cx
    let n := step (half a.s.ct nt) nt m.1 m.2
    ((AITER a).2.1 = false → (AITER a).1.s = a.s) ∧
    ((AITER a).2.1 = true → (AITER a).1.s = ⟨a.s.ct, a.s.cy, nt, n.1, n.2⟩) := by
  simp only [aiter]
  split <;> rename_i h <;> constructor <;> intro hacc <;> simp_all

/-- every trial ends at `min (curr_t + h) tEnd ≤ tEnd`, so accepted steps stay inside `[ts[0], ts[-1]]` -/
theorem trial_end_le (a : ASt T Y X) : pmin (add a.s.ct a.h) tEnd ≤ tEnd := by
  rw [pmin_eq_min]; exact min_le_right _ _

/-- the three solver calls of a trial are over `[t, next]`, `[t, mid]`, `[mid, next]` -/
theorem trial_queries (a : ASt T Y X) :
    (AITER a).2.2 = [(a.s.ct, pmin (add a.s.ct a.h) tEnd),
                     (a.s.ct, half a.s.ct (pmin (add a.s.ct a.h) tEnd)),
                     (half a.s.ct (pmin (add a.s.ct a.h) tEnd), pmin (add a.s.ct a.h) tEnd)] := by
  simp only [aiter]

/-- relational semantics of the adaptive `while` loop, recording the accepted steps -/
inductive AReaches : T → ASt T Y X → ASt T Y X → List (T × T) → Prop
  | stop {out a} : ¬ a.s.ct < out → AReaches out a a []
  | rej {out a a' acc} : a.s.ct < out → (AITER a).2.1 = false → AReaches out (AITER a).1 a' acc →
      AReaches out a a' acc
  | acc {out a a' acc} : a.s.ct < out → (AITER a).2.1 = true → AReaches out (AITER a).1 a' acc →
      AReaches out a a' ((a.s.ct, pmin (add a.s.ct a.h) tEnd) :: acc)

variable {tEnd step add half err update dtMin one}

/-- **Accepted steps are contiguous** from the entry time to the exit time. -/
theorem accepted_tile {out : T} {a a' : ASt T Y X} {acc}
    (h : AReaches tEnd step add half err update dtMin one out a a' acc) : ChainLog a.s.ct acc a'.s.ct := by
  induction h with
  | stop _ => rfl
  | @rej a a' acc _ hrej _ ih =>
      have := (trial_effect tEnd step add half err update dtMin one a).1 hrej
      rw [this] at ih; exact ih
  | @acc a a' acc _ hacc _ ih =>
      have := (trial_effect tEnd step add half err update dtMin one a).2 hacc
      rw [this] at ih; exact ⟨rfl, ih⟩

/-- **… stay inside the interval and end exactly at `ts[-1]`.** -/
theorem accepted_end {a a' : ASt T Y X} {acc}
    (h : AReaches tEnd step add half err update dtMin one tEnd a a' acc) (ha : a.s.ct ≤ tEnd) : a'.s.ct = tEnd := by
  have hle : a'.s.ct ≤ tEnd := by
    induction h with
    | stop _ => exact ha
    | @rej a a' acc _ hrej _ ih =>
        apply ih; rw [(trial_effect tEnd step add half err update dtMin one a).1 hrej]; exact ha
    | @acc a a' acc _ hacc _ ih =>
        apply ih; rw [(trial_effect tEnd step add half err update dtMin one a).2 hacc]
        exact trial_end_le tEnd add a
  have hge : ¬ a'.s.ct < tEnd := by
    clear hle ha
    induction h with
    | stop h => exact h
    | rej _ _ _ ih => exact ih
    | acc _ _ _ ih => exact ih
  exact le_antisymm hle (not_lt.mp hge)

/-- the step size used by every trial after the first is ≥ `dt_min`; for the first one this is the
hypothesis `dt_min ≤ dt` (the proof needs it: see finding F7 for what the real code does when it fails). -/
theorem trial_ge_dtmin {out : T} {a a' : ASt T Y X} {acc}
    (h : AReaches tEnd step add half err update dtMin one out a a' acc) (ha : dtMin ≤ a.h) : dtMin ≤ a'.h := by
  induction h with
  | stop _ => exact ha
  | rej _ _ _ ih => exact ih (h_ge_dtmin tEnd step add half err update dtMin one _)
  | acc _ _ _ ih => exact ih (h_ge_dtmin tEnd step add half err update dtMin one _)

end loop

/-! ### arithmetic facts about a single trial over an ordered field -/
section arith
variable {K : Type} [Field K] [LinearOrder K] [IsStrictOrderedRing K]

/-- a trial strictly advances time, and its length is `≥ dt_min` unless it is clipped to end at `ts[-1]`. -/
theorem trial_length (ct h tEnd dtMin : K) (hpos : 0 < dtMin) (hh : dtMin ≤ h) (hct : ct < tEnd) :
    ct < pmin (ct + h) tEnd ∧ (dtMin ≤ pmin (ct + h) tEnd - ct ∨ pmin (ct + h) tEnd = tEnd) := by
  rw [pmin_eq_min]
  constructor
  · exact lt_min (by linarith) hct
  · rcases le_total (ct + h) tEnd with hle | hle
    · left; rw [min_eq_left hle]; linarith
    · right; exact min_eq_right hle

/-- the mid point of a trial lies strictly inside it -/
theorem half_inside (ct nt : K) (h : ct < nt) : ct < (1 / 2) * (ct + nt) ∧ (1 / 2) * (ct + nt) < nt := by
  constructor <;> linarith

end arith
end C14
