/-
C12 — outputs lie on one dt-grid trajectory: interpolation and output-time invariance (fixed steps).

Model: `Model/Loop.lean` (hand-written, tied to the real `BaseSDESolver.integrate` by the correspondence check
vlib/corr_loop.py); `linear_interp` is regenerated from torchsde/_core/interp.py.
Times are an arbitrary linear order and `plus` (t ↦ t + dt) an arbitrary function in the invariance theorems, so they
hold verbatim for IEEE doubles; the closed form of the grid is proved over ordered fields.
-/
import Tsv.Proofs.LoopCore
import Tsv.Gen.Loop
import Mathlib.Tactic.Ring
import Mathlib.Tactic.FieldSimp
import Mathlib.Tactic.Linarith
import Mathlib.Algebra.Order.Field.Basic

namespace C12
open Model.Loop LoopCore

section order
variable {T Y X : Type} [LinearOrder T]
variable {plus : T → T} {tEnd : T} {step : T → T → Y → X → Y × X} {interp : T → Y → T → Y → T → Y}

/-- what `integrate` returns, relationally -/
def Run (plus : T → T) (tEnd : T) (step : T → T → Y → X → Y × X) (interp : T → Y → T → Y → T → Y)
    (y0 : Y) (t0 : T) (rest : List T) (x0 : X) (ys : List Y) (sf : St T Y X) (lg : List (T × T)) : Prop :=
  ∃ ys', ys = y0 :: ys' ∧
    Outs (plus := plus) (tEnd := tEnd) (step := step) (interp := interp) rest ⟨t0, y0, t0, y0, x0⟩ ys' sf lg

/-- the executable model refines the relational one -/
theorem integrate_run {fuel y0 t0 rest x0 ys sf lg}
    (h : integrate plus tEnd step interp fuel y0 t0 rest x0 = some (ys, sf, lg)) :
    Run plus tEnd step interp y0 t0 rest x0 ys sf lg := by
  unfold integrate at h
  split at h
  · simp at h
  · rename_i ys' sf' lf' ho
    simp only [Option.some.injEq, Prod.mk.injEq] at h
    obtain ⟨rfl, rfl, rfl⟩ := h
    obtain ⟨l, e, o⟩ := outputs_outs fuel rest _ [] ho
    simp at e
    exact ⟨ys', rfl, e ▸ o⟩

/-- `ys[0]` is `y0` exactly, and there is one output per requested time. -/
theorem ys0_eq_and_length {y0 t0 rest x0 ys sf lg} (h : Run plus tEnd step interp y0 t0 rest x0 ys sf lg)
    (hs : rest.Pairwise (· ≤ ·)) : ys.head? = some y0 ∧ ys.length = rest.length + 1 := by
  obtain ⟨ys', rfl, o⟩ := h
  exact ⟨rfl, by simp [(outs_spec o hs).1]⟩

/-- **Output-time invariance.** Two runs from the same `(y0, t0, extra)` with the same last time (hence the same
clipping point) but otherwise arbitrary sorted output times return the same value at every time they share:
adding, removing or moving intermediate output times never changes the others. -/
theorem output_time_invariance {y0 t0 x0} {rest rest' : List T} {ys ys' sf sf' lg lg'}
    (h : Run plus tEnd step interp y0 t0 rest x0 ys sf lg) (h' : Run plus tEnd step interp y0 t0 rest' x0 ys' sf' lg')
    (hs : rest.Pairwise (· ≤ ·)) (hs' : rest'.Pairwise (· ≤ ·))
    (i j : Nat) (hi : i < rest.length) (hj : j < rest'.length) (hij : rest[i] = rest'[j])
    (hyi : i + 1 < ys.length) (hyj : j + 1 < ys'.length) : ys[i + 1] = ys'[j + 1] := by
  obtain ⟨a, rfl, o⟩ := h
  obtain ⟨b, rfl, o'⟩ := h'
  obtain ⟨hl, ha⟩ := outs_spec o hs
  obtain ⟨hl', hb⟩ := outs_spec o' hs'
  obtain ⟨s1, l1, r1, e1⟩ := ha i hi (by simpa using hyi)
  obtain ⟨s2, l2, r2, e2⟩ := hb j hj (by simpa using hyj)
  rw [hij] at r1 e1
  obtain ⟨rfl, _⟩ := reaches_functional r1 r2
  simp only [List.getElem_cons_succ]
  rw [e1, e2]

/-- **One trajectory.** The sequence of solver steps (= Brownian queries) of a run is the sequence of a direct run to
`ts[-1]`: it tiles `[t0, ts[-1]]` contiguously, ends exactly at `ts[-1]`, and does not depend on the interior
output times. -/
theorem queries_tile {y0 t0 x0} {rest : List T} {ys sf lg} (h : Run plus tEnd step interp y0 t0 rest x0 ys sf lg)
    (hs : rest.Pairwise (· ≤ ·)) (hlast : rest.getLast? = some tEnd) (h0 : t0 ≤ tEnd) :
    Reaches plus tEnd step tEnd ⟨t0, y0, t0, y0, x0⟩ sf lg ∧ ChainLog t0 lg tEnd ∧ sf.ct = tEnd := by
  obtain ⟨a, rfl, o⟩ := h
  have r := outs_log o hs tEnd hlast
  have e := reaches_end_exact r h0
  exact ⟨r, e ▸ reaches_chain r, e⟩

theorem log_indep_of_outputs {y0 t0 x0} {rest rest' : List T} {ys ys' sf sf' lg lg'}
    (h : Run plus tEnd step interp y0 t0 rest x0 ys sf lg) (h' : Run plus tEnd step interp y0 t0 rest' x0 ys' sf' lg')
    (hs : rest.Pairwise (· ≤ ·)) (hs' : rest'.Pairwise (· ≤ ·))
    (hl : rest.getLast? = some tEnd) (hl' : rest'.getLast? = some tEnd) : lg = lg' ∧ sf = sf' := by
  obtain ⟨a, rfl, o⟩ := h
  obtain ⟨b, rfl, o'⟩ := h'
  obtain ⟨e1, e2⟩ := reaches_functional (outs_log o hs tEnd hl) (outs_log o' hs' tEnd hl')
  exact ⟨e2, e1⟩

/-- an output is always the interpolant between the last two grid states (`prev`, `curr`) bracketing it:
`prev_t < out_t ≤ curr_t` whenever at least one step was taken to reach it. -/
theorem out_between {out : T} {s s' : St T Y X} {lg} (h : Reaches plus tEnd step out s s' lg) (hne : lg ≠ []) :
    s'.pt < out ∧ ¬ s'.ct < out := by
  refine ⟨?_, reaches_exit h⟩
  induction h with
  | stop _ => exact absurd rfl hne
  | step hlt hr ih =>
      cases hr with
      | stop _ => simpa [iter] using hlt
      | step h1 h2 => exact ih (by simp)

end order

/-! ### the regenerated `linear_interp` -/
section interp
variable {K : Type} [Field K] [LinearOrder K]

/-- an output at a grid time is the grid state -/
theorem interp_at_right (t0 t1 y0 y1 : K) (h : t1 - t0 ≠ 0) : Gen.linear_interp_y_0_0 t0 t1 t1 y0 y1 = y1 := by
  simp only [Gen.linear_interp_y_0_0]; field_simp; ring

theorem interp_at_left (t0 t1 y0 y1 : K) (h : t1 - t0 ≠ 0) : Gen.linear_interp_y_0_0 t0 t1 t0 y0 y1 = y0 := by
  simp only [Gen.linear_interp_y_0_0]; field_simp; ring

/-- it IS the linear interpolant: affine in `t`, through both end points -/
theorem interp_linear (t0 t1 t y0 y1 : K) (h : t1 - t0 ≠ 0) :
    Gen.linear_interp_y_0_0 t0 t1 t y0 y1 = y0 + (t - t0) / (t1 - t0) * (y1 - y0) := by
  simp only [Gen.linear_interp_y_0_0]; field_simp; ring

end interp

/-! ### closed form of the grid over an ordered field -/
section grid
set_option linter.unusedSectionVars false
variable {K Y X : Type} [Field K] [LinearOrder K] [IsStrictOrderedRing K]

/-- the grid walked by the fixed-step loop: `g 0 = t0`, `g (k+1) = min (g k + dt) tEnd` -/
def grid (dt tEnd t0 : K) : Nat → K
  | 0 => t0
  | k + 1 => pmin (grid dt tEnd t0 k + dt) tEnd

/-- `g k = min (t0 + k·dt) tEnd`: the grid is `ts[0] + k dt` with the last step clipped to `ts[-1]`. -/
theorem grid_closed (dt tEnd t0 : K) (hdt : 0 ≤ dt) (h0 : t0 ≤ tEnd) (k : Nat) :
    grid dt tEnd t0 k = min (t0 + k * dt) tEnd := by
  induction k with
  | zero => simp [grid, h0]
  | succ k ih =>
      simp only [grid, ih, pmin_eq_min, Nat.cast_succ]
      rcases le_total (t0 + k * dt) tEnd with h | h
      · rw [min_eq_left h]; congr 1; ring
      · rw [min_eq_right h]
        have : tEnd ≤ t0 + (k + 1) * dt := by nlinarith
        rw [min_eq_right this, min_eq_right (by linarith)]

/-- the loop state after `k` iterations sits on that grid -/
theorem iter_on_grid (dt tEnd : K) (step : K → K → Y → X → Y × X) (s : St K Y X) (k : Nat) :
    ((iter (fun c => c + dt) tEnd step)^[k] s).ct = grid dt tEnd s.ct k := by
  induction k generalizing s with
  | zero => rfl
  | succ k ih =>
      rw [Function.iterate_succ', Function.comp_apply]
      simp only [iter, grid]
      rw [ih]

end grid
end C12
