/-
C04 — the law of Brownian motion at the level of the Brownian TREE: every node of every well-formed tree.

`C04Alg.split_law` is about ONE bridge split: if the parent's `(W, H)` are uncorrelated with variances `(h, h/12)` and the two fresh
normals are standard and uncorrelated with everything, the children have exactly the Brownian covariance structure, for every split
ratio.  Here that step is iterated down the tree of the hand-written object model (`Model/Brownian.lean`, tied to the real class by
the per-query correspondence):

* random variables are elements of an arbitrary `K`-module `R` carrying a symmetric bilinear form `ip` (their covariance) - for the
  real object: the coefficient vectors over its independent noise draws, which is what the one-hot oracle of the C04 check reads off
  the real `BrownianInterval`;
* `vecOps` is the bridge split acting on such vectors: by `C04.split_linear` the regenerated scalar kernel IS this linear map
  (`vecOps_coordinatewise`: applied coordinate by coordinate to coefficient vectors it is the regenerated kernel itself);
* `node_law`: in ANY well-formed tree (any shape, any split points, any depth), with orthonormal fresh noise per node and a root
  `(W, H)` of variances `(T, T/12)`, EVERY node `[s, e]` has `Var W = e - s`, `Var H = (e - s)/12`, `Cov(W, H) = 0`, and is
  uncorrelated with all noise that is not drawn strictly above it (so that the step can be iterated);
* `disjoint_law` (independent increments): two nodes whose paths diverge - disjoint intervals - have all four cross covariances zero;
* `query_var`: for EVERY interval `[ta, tb]` the tree resolves, the sum of the `W`-values of the pieces `find` selects (= the `W` the
  query returns, `C03Model.answerSpec_W`) has variance exactly `tb - ta`, whatever the shape of the tree, i.e. whatever was queried
  before; `query_cov` / `query_WU`: the same for arbitrary linear node functionals whose single-node covariance telescopes, in
  particular the complete second moments of what a query returns: `Var W = h`, `Cov(W, U) = h²/2`, `Var U = h³/3`, `h = tb - ta`
  (`ψU tb` is the Chen weight `C03Model.φU`, whose sum over the pieces is the returned `U`, `C03Model.answerSpec_U`);
* `queries_uncorrelated`: two resolved queries `[ta,tb]`, `[tc,td]` with `tb ≤ tc` of one tree have uncorrelated `W` and `U` (any linear
  functionals of their pieces) - independent increments at the level of what the object returns; with C03 (additivity for every
  history) this fixes the covariance of ANY two increments at resolved times to the length of the overlap: `overlap_cov`
  (`Cov(W(s,t'), W(u,v)) = t' - u` for `s < u < t' < v`), the defining covariance structure of Brownian motion;
* `C04ModelEx`: every hypothesis is met over ℝ (real square root, coefficient vectors with the dot product, one-hot noise).

That Gaussian vectors are determined by these second moments is classical and trusted (DESIGN §5).
-/
import Tsv.Proofs.C04Alg
import Tsv.Proofs.BMCore
import Tsv.Proofs.C03Model
import Mathlib.Algebra.Module.Basic
import Mathlib.Algebra.Module.Pi

namespace C04Model
open Model.BM BMCore
set_option linter.unusedSectionVars false

variable {K R : Type} [Field K] [LinearOrder K] [IsStrictOrderedRing K] [AddCommGroup R] [Module K R]

/-- a symmetric bilinear form on the random variables: their covariance -/
structure Cov (K R : Type) [Field K] [AddCommGroup R] [Module K R] where
  ip : R → R → K
  add_left : ∀ x y z, ip (x + y) z = ip x z + ip y z
  smul_left : ∀ (a : K) x z, ip (a • x) z = a * ip x z
  symm : ∀ x y, ip x y = ip y x

namespace Cov
variable (C : Cov K R)
theorem add_right (x y z : R) : C.ip x (y + z) = C.ip x y + C.ip x z := by
  rw [C.symm, C.add_left, C.symm y, C.symm z]
theorem smul_right (a : K) (x z : R) : C.ip x (a • z) = a * C.ip x z := by
  rw [C.symm, C.smul_left, C.symm]
end Cov

/-- a linear combination of the four coordinates of one split -/
def lin (c : K × K × K × K) (W H X1 X2 : R) : R := c.1 • W + c.2.1 • H + c.2.2.1 • X1 + c.2.2.2 • X2

/-- coefficient vector of a scalar kernel -/
def coefs (f : K → K → K → K → K) : K × K × K × K := (f 1 0 0 0, f 0 1 0 0, f 0 0 1 0, f 0 0 0 1)

/-- the covariance of two linear combinations of `(W, H, X1, X2)` with Gram matrix `diag(h, h/12, 1, 1)` is `cov4` -/
theorem ip_lin (C : Cov K R) (f g : K → K → K → K → K) (W H X1 X2 : R) (h : K)
    (hWW : C.ip W W = h) (hHH : C.ip H H = h / 12) (hWH : C.ip W H = 0)
    (h11 : C.ip X1 X1 = 1) (h22 : C.ip X2 X2 = 1) (h12 : C.ip X1 X2 = 0)
    (hW1 : C.ip W X1 = 0) (hW2 : C.ip W X2 = 0) (hH1 : C.ip H X1 = 0) (hH2 : C.ip H X2 = 0) :
    C.ip (lin (coefs f) W H X1 X2) (lin (coefs g) W H X1 X2) = C04.cov4 f g h := by
  have sHW := (C.symm H W).trans hWH
  have s21 := (C.symm X2 X1).trans h12
  have s1W := (C.symm X1 W).trans hW1
  have s2W := (C.symm X2 W).trans hW2
  have s1H := (C.symm X1 H).trans hH1
  have s2H := (C.symm X2 H).trans hH2
  simp only [lin, coefs, C.add_left, C.smul_left, C.add_right, C.smul_right, hWW, hHH, hWH, h11, h22, h12, hW1, hW2, hH1, hH2,
    sHW, s21, s1W, s2W, s1H, s2H, C04.cov4]
  ring

/-- covariance of a linear combination with a vector uncorrelated with all four coordinates -/
theorem ip_lin_orth (C : Cov K R) (c : K × K × K × K) (W H X1 X2 z : R)
    (hW : C.ip W z = 0) (hH : C.ip H z = 0) (h1 : C.ip X1 z = 0) (h2 : C.ip X2 z = 0) :
    C.ip (lin c W H X1 X2) z = 0 := by
  simp only [lin, C.add_left, C.smul_left, hW, hH, h1, h2]; ring

variable (sqrt : K → K)

/-- the bridge split acting on random variables (space-time Levy area mode) -/
def vecOps (nz : Path → Bool → R) : Ops K R where
  haveH := true
  bridge := fun s m e isLeft par x1 x2 =>
    if isLeft then (lin (coefs (Gen.split_HL_W sqrt s m e)) par.1 par.2 x1 x2, lin (coefs (Gen.split_HL_H sqrt s m e)) par.1 par.2 x1 x2)
    else (lin (coefs (Gen.split_HR_W sqrt s m e)) par.1 par.2 x1 x2, lin (coefs (Gen.split_HR_H sqrt s m e)) par.1 par.2 x1 x2)
  noise := nz
  zero := 0
  -- the aggregation step and `_H_to_U` of the object (`Model.aggStep`, `Model.toU`) acting on random variables
  agg := fun ta acc s e v =>
    (acc.1 + v.1, (1 / (e - ta)) • ((e - s) • (v.2 + (1 / 2 : K) • acc.1) + (s - ta) • (acc.2 - (1 / 2 : K) • v.1)))
  toU := fun wh ta tb => (tb - ta) • ((1 / 2 : K) • wh.1 + wh.2)

/-- **tie to the regenerated kernels**: on coefficient vectors (`R = ι → K`) the vector-valued split is the regenerated scalar kernel
applied coordinate by coordinate. -/
theorem vecOps_coordinatewise {ι : Type} (nz : Path → Bool → (ι → K)) (s m e : K) (par : (ι → K) × (ι → K)) (x1 x2 : ι → K) (i : ι) :
    ((vecOps sqrt nz).bridge s m e true par x1 x2).1 i = Gen.split_HL_W sqrt s m e (par.1 i) (par.2 i) (x1 i) (x2 i) ∧
    ((vecOps sqrt nz).bridge s m e true par x1 x2).2 i = Gen.split_HL_H sqrt s m e (par.1 i) (par.2 i) (x1 i) (x2 i) ∧
    ((vecOps sqrt nz).bridge s m e false par x1 x2).1 i = Gen.split_HR_W sqrt s m e (par.1 i) (par.2 i) (x1 i) (x2 i) ∧
    ((vecOps sqrt nz).bridge s m e false par x1 x2).2 i = Gen.split_HR_H sqrt s m e (par.1 i) (par.2 i) (x1 i) (x2 i) := by
  obtain ⟨h1, h2, h3, h4⟩ := C04.split_linear sqrt s m e (par.1 i) (par.2 i) (x1 i) (x2 i)
  refine ⟨?_, ?_, ?_, ?_⟩
  · rw [h1]; simp [vecOps, lin, coefs]
  · rw [h2]; simp [vecOps, lin, coefs]
  · rw [h3]; simp [vecOps, lin, coefs]
  · rw [h4]; simp [vecOps, lin, coefs]

variable (C : Cov K R) (nz : Path → Bool → R)

/-- `q` is a strict prefix of `p` -/
def StrictPrefix (q p : Path) : Prop := ∃ r, r ≠ [] ∧ q ++ r = p

/-- fresh standard noise per node -/
structure NoiseON : Prop where
  unit : ∀ p b, C.ip (nz p b) (nz p b) = 1
  orth : ∀ p b q b', (p, b) ≠ (q, b') → C.ip (nz p b) (nz q b') = 0

/-- the Brownian second moments of a node value over `[s, e]` -/
def LawAt (v : R × R) (s e : K) : Prop :=
  C.ip v.1 v.1 = e - s ∧ C.ip v.2 v.2 = (e - s) / 12 ∧ C.ip v.1 v.2 = 0

/-- the value at absolute path `pre` is uncorrelated with all noise not drawn strictly above it -/
def Fresh (v : R × R) (pre : Path) : Prop :=
  ∀ q b, ¬ StrictPrefix q pre → C.ip v.1 (nz q b) = 0 ∧ C.ip v.2 (nz q b) = 0

theorem strictPrefix_snoc {q pre : Path} {b : Bool} (h : ¬ StrictPrefix q (pre ++ [b])) : q ≠ pre ∧ ¬ StrictPrefix q pre := by
  constructor
  · rintro rfl; exact h ⟨[b], by simp, rfl⟩
  · rintro ⟨r, hr, rfl⟩; exact h ⟨r ++ [b], by simp, by simp⟩

/-- one bridge split preserves the law and the freshness invariant, for either child -/
theorem child_law (hsq : ∀ x : K, 0 ≤ x → sqrt x * sqrt x = x) (hn : NoiseON C nz) {s m e : K} (hsm : s < m) (hme : m < e)
    {par : R × R} {pre : Path} (hl : LawAt C par s e) (hf : Fresh C nz par pre) (isLeft : Bool) :
    LawAt C ((vecOps sqrt nz).bridge s m e isLeft par (nz pre false) (nz pre true)) (if isLeft then s else m) (if isLeft then m else e) ∧
    Fresh C nz ((vecOps sqrt nz).bridge s m e isLeft par (nz pre false) (nz pre true)) (pre ++ [!isLeft]) := by
  obtain ⟨hWW, hHH, hWH⟩ := hl
  have hself : ¬ StrictPrefix pre pre := by
    rintro ⟨r, hr, h⟩
    have : (pre ++ r).length = pre.length := by rw [h]
    simp at this; exact hr this
  obtain ⟨f1a, f1b⟩ := hf pre false hself
  obtain ⟨f2a, f2b⟩ := hf pre true hself
  have h12 : C.ip (nz pre false) (nz pre true) = 0 := hn.orth _ _ _ _ (by simp)
  have hl0 : 0 < m - s := sub_pos.mpr hsm
  have hr0 : 0 < e - m := sub_pos.mpr hme
  have law := C04.split_law sqrt s (m - s) (e - m) hl0 hr0 hsq
  simp only [show s + (m - s) = m by ring, show m + (e - m) = e by ring, show m - s + (e - m) = e - s by ring] at law
  obtain ⟨l1, l2, l3, l4, l5, l6, _, _, _, _⟩ := law
  have key := fun f g => ip_lin C f g par.1 par.2 (nz pre false) (nz pre true) (e - s) hWW hHH hWH (hn.unit _ _) (hn.unit _ _) h12
    f1a f2a f1b f2b
  constructor
  · cases isLeft
    · simp only [vecOps, LawAt, Bool.false_eq_true, if_false]
      exact ⟨(key _ _).trans l4, (key _ _).trans l5, (key _ _).trans l6⟩
    · simp only [vecOps, LawAt, if_true]
      exact ⟨(key _ _).trans l1, (key _ _).trans l2, (key _ _).trans l3⟩
  · intro q b hq
    obtain ⟨hne, hnp⟩ := strictPrefix_snoc hq
    obtain ⟨o1, o2⟩ := hf q b hnp
    have n1 : C.ip (nz pre false) (nz q b) = 0 := hn.orth _ _ _ _ (by intro h; exact hne (Prod.mk.inj h).1.symm)
    have n2 : C.ip (nz pre true) (nz q b) = 0 := hn.orth _ _ _ _ (by intro h; exact hne (Prod.mk.inj h).1.symm)
    cases isLeft <;> simp only [vecOps, Bool.false_eq_true, if_false, if_true] <;>
      exact ⟨ip_lin_orth C _ _ _ _ _ _ o1 o2 n1 n2, ip_lin_orth C _ _ _ _ _ _ o1 o2 n1 n2⟩

variable {c : Cfg K}

/-- **C04, every node of every tree.**  In any well-formed tree, whatever its shape and split points: if the value `top` of the subtree's
root has the Brownian second moments over `[t.s, t.e]` and is fresh, then so has the value of every node below it. -/
theorem node_law (hsq : ∀ x : K, 0 ≤ x → sqrt x * sqrt x = x) (hn : NoiseON C nz) :
    ∀ (t : Model.BM.Tree K) (top : R × R) (p pre : Path) {v : R × R} {nd : Model.BM.Tree K}, WF c t → LawAt C top t.s t.e → Fresh C nz top pre →
      valueAt (vecOps sqrt nz) top t p pre = some v → t.get? p = some nd → LawAt C v nd.s nd.e ∧ Fresh C nz v (pre ++ p)
  | t, top, [], pre, v, nd, _, hl, hf, hv, hg => by
      have e1 : v = top := by cases t <;> simpa [valueAt] using hv.symm
      have e2 : nd = t := by cases t <;> simpa [Tree.get?] using hg.symm
      subst e1 e2
      exact ⟨hl, by simpa using hf⟩
  | Model.BM.Tree.leaf _ _, _, _ :: _, _, _, _, _, _, _, hv, _ => by simp [valueAt] at hv
  | Model.BM.Tree.node s e m l r, top, b :: p, pre, v, nd, hwf, hl, hf, hv, hg => by
      obtain ⟨hsm, hme, _, hls, hle, hrs, hre, hwl, hwr⟩ := hwf
      simp only [valueAt] at hv
      simp only [Tree.s, Tree.e] at hl
      obtain ⟨cl, cf⟩ := child_law sqrt C nz hsq hn hsm hme hl hf (!b)
      simp only [Bool.not_not] at cf
      cases b
      · simp only [Bool.not_false, if_true] at cl
        simp only [Tree.get?, Bool.false_eq_true, if_false] at hg
        simp only [Bool.not_false, Bool.false_eq_true, if_false] at hv
        have := node_law hsq hn l _ p (pre ++ [false]) hwl (by rw [hls, hle]; exact cl) cf hv hg
        simpa using this
      · simp only [Bool.not_true, Bool.false_eq_true, if_false] at cl
        simp only [Tree.get?, if_true] at hg
        simp only [Bool.not_true, if_true] at hv
        have := node_law hsq hn r _ p (pre ++ [true]) hwr (by rw [hrs, hre]; exact cl) cf hv hg
        simpa using this

/-! ### independent increments: disjoint nodes are uncorrelated -/

/-- everything below a node is a linear combination of the node's value and of the noise drawn at or below it: a vector uncorrelated
with those is uncorrelated with every descendant -/
theorem desc_orth : ∀ (t : Model.BM.Tree K) (top : R × R) (p pre : Path) {v : R × R} (z : R),
    valueAt (vecOps sqrt nz) top t p pre = some v → C.ip top.1 z = 0 → C.ip top.2 z = 0 →
    (∀ q b, pre <+: q → C.ip (nz q b) z = 0) → C.ip v.1 z = 0 ∧ C.ip v.2 z = 0
  | t, top, [], pre, v, z, hv, h1, h2, _ => by
      have e1 : v = top := by cases t <;> simpa [valueAt] using hv.symm
      subst e1; exact ⟨h1, h2⟩
  | Model.BM.Tree.leaf _ _, _, _ :: _, _, _, _, hv, _, _, _ => by simp [valueAt] at hv
  | Model.BM.Tree.node s e m l r, top, b :: p, pre, v, z, hv, h1, h2, hn => by
      simp only [valueAt] at hv
      have n1 := hn pre false (List.prefix_refl _)
      have n2 := hn pre true (List.prefix_refl _)
      have hn' : ∀ q b', (pre ++ [b]) <+: q → C.ip (nz q b') z = 0 := fun q b' hq =>
        hn q b' (List.IsPrefix.trans (List.prefix_append _ _) hq)
      cases b
      · simp only [Bool.not_false, Bool.false_eq_true, if_false] at hv
        exact desc_orth l _ p (pre ++ [false]) z hv
          (by simp only [vecOps, if_true]; exact ip_lin_orth C _ _ _ _ _ _ h1 h2 n1 n2)
          (by simp only [vecOps, if_true]; exact ip_lin_orth C _ _ _ _ _ _ h1 h2 n1 n2) hn'
      · simp only [Bool.not_true, if_true] at hv
        exact desc_orth r _ p (pre ++ [true]) z hv
          (by simp only [vecOps, Bool.false_eq_true, if_false]; exact ip_lin_orth C _ _ _ _ _ _ h1 h2 n1 n2)
          (by simp only [vecOps, Bool.false_eq_true, if_false]; exact ip_lin_orth C _ _ _ _ _ _ h1 h2 n1 n2) hn'

theorem not_strictPrefix_of_diverge {a q r : Path} {b : Bool} (hq : (a ++ [b]) <+: q) : ¬ StrictPrefix q (a ++ [!b] ++ r) := by
  rintro ⟨u, _, hu⟩
  obtain ⟨w, rfl⟩ := hq
  have : (a ++ [b] ++ w ++ u)[a.length]? = (a ++ [!b] ++ r)[a.length]? := by rw [hu]
  simp [List.getElem?_append_left, List.getElem?_append_right] at this

/-- **independent increments at one node**: below a node `[s,e]` split at `m`, every node of the left subtree is uncorrelated (W and H,
all four combinations) with every node of the right subtree. -/
theorem diverge_law (hsq : ∀ x : K, 0 ≤ x → sqrt x * sqrt x = x) (hn : NoiseON C nz) {s m e : K} {l r : Model.BM.Tree K}
    (hwf : WF c (Model.BM.Tree.node s e m l r)) {top : R × R} {a p1 p2 : Path} {d1 d2 : R × R} {n1 n2 : Model.BM.Tree K}
    (hl : LawAt C top s e) (hf : Fresh C nz top a)
    (h1 : valueAt (vecOps sqrt nz) top (Model.BM.Tree.node s e m l r) (false :: p1) a = some d1)
    (h2 : valueAt (vecOps sqrt nz) top (Model.BM.Tree.node s e m l r) (true :: p2) a = some d2)
    (g1 : l.get? p1 = some n1) (g2 : r.get? p2 = some n2) :
    C.ip d1.1 d2.1 = 0 ∧ C.ip d1.1 d2.2 = 0 ∧ C.ip d1.2 d2.1 = 0 ∧ C.ip d1.2 d2.2 = 0 := by
  obtain ⟨hsm, hme, _, hls, hle, hrs, hre, hwl, hwr⟩ := hwf
  simp only [valueAt, Bool.not_false, Bool.not_true, Bool.false_eq_true, if_false, if_true] at h1 h2
  -- the two children
  obtain ⟨lawL, freshL⟩ := child_law sqrt C nz hsq hn hsm hme hl hf true
  obtain ⟨lawR, freshR⟩ := child_law sqrt C nz hsq hn hsm hme hl hf false
  simp only [Bool.not_true, Bool.not_false, if_true, Bool.false_eq_true, if_false] at lawL freshL lawR freshR
  -- their cross covariances (split_law)
  obtain ⟨hWW, hHH, hWH⟩ := hl
  have hself : ¬ StrictPrefix a a := by
    rintro ⟨u, hu, h⟩
    have : (a ++ u).length = a.length := by rw [h]
    simp at this; exact hu this
  obtain ⟨f1a, f1b⟩ := hf a false hself
  obtain ⟨f2a, f2b⟩ := hf a true hself
  have h12 : C.ip (nz a false) (nz a true) = 0 := hn.orth _ _ _ _ (by simp)
  have law := C04.split_law sqrt s (m - s) (e - m) (sub_pos.mpr hsm) (sub_pos.mpr hme) hsq
  simp only [show s + (m - s) = m by ring, show m + (e - m) = e by ring, show m - s + (e - m) = e - s by ring] at law
  obtain ⟨_, _, _, _, _, _, x1, x2, x3, x4⟩ := law
  have key := fun f g => ip_lin C f g top.1 top.2 (nz a false) (nz a true) (e - s) hWW hHH hWH (hn.unit _ _) (hn.unit _ _) h12
    f1a f2a f1b f2b
  set vL := (vecOps sqrt nz).bridge s m e true top (nz a false) (nz a true) with hvL
  set vR := (vecOps sqrt nz).bridge s m e false top (nz a false) (nz a true) with hvR
  have c11 : C.ip vL.1 vR.1 = 0 := by simp only [hvL, hvR, vecOps, if_true, Bool.false_eq_true, if_false]; exact (key _ _).trans x1
  have c12 : C.ip vL.1 vR.2 = 0 := by simp only [hvL, hvR, vecOps, if_true, Bool.false_eq_true, if_false]; exact (key _ _).trans x2
  have c21 : C.ip vL.2 vR.1 = 0 := by simp only [hvL, hvR, vecOps, if_true, Bool.false_eq_true, if_false]; exact (key _ _).trans x3
  have c22 : C.ip vL.2 vR.2 = 0 := by simp only [hvL, hvR, vecOps, if_true, Bool.false_eq_true, if_false]; exact (key _ _).trans x4
  -- step 1: every node below the right child is uncorrelated with the left child
  have stepR : ∀ z, C.ip vR.1 z = 0 → C.ip vR.2 z = 0 → (∀ q b, (a ++ [true]) <+: q → C.ip (nz q b) z = 0) →
      C.ip d2.1 z = 0 ∧ C.ip d2.2 z = 0 := fun z => desc_orth sqrt C nz r vR p2 (a ++ [true]) z h2
  have nzL : ∀ (i : Bool) q b, (a ++ [true]) <+: q → C.ip (nz q b) (if i then vL.1 else vL.2) = 0 := by
    intro i q b hq
    have := freshL q b (by simpa using not_strictPrefix_of_diverge (r := []) hq)
    cases i
    · simp only [Bool.false_eq_true, if_false]; rw [C.symm]; exact this.2
    · simp only [if_true]; rw [C.symm]; exact this.1
  obtain ⟨r11, r21⟩ := stepR vL.1 ((C.symm _ _).trans c11) ((C.symm _ _).trans c12) (fun q b hq => by simpa using nzL true q b hq)
  obtain ⟨r12, r22⟩ := stepR vL.2 ((C.symm _ _).trans c21) ((C.symm _ _).trans c22) (fun q b hq => by simpa using nzL false q b hq)
  -- freshness of the right descendant: uncorrelated with all noise at or below the left child
  obtain ⟨_, freshD2⟩ := node_law sqrt C nz hsq hn r vR p2 (a ++ [true]) hwr (by rw [hrs, hre]; exact lawR) freshR h2 g2
  have nzD : ∀ (i : Bool) q b, (a ++ [false]) <+: q → C.ip (nz q b) (if i then d2.1 else d2.2) = 0 := by
    intro i q b hq
    have := freshD2 q b (by simpa using not_strictPrefix_of_diverge (r := p2) hq)
    cases i
    · simp only [Bool.false_eq_true, if_false]; rw [C.symm]; exact this.2
    · simp only [if_true]; rw [C.symm]; exact this.1
  -- step 2: every node below the left child is uncorrelated with the right descendant
  have stepL : ∀ z, C.ip vL.1 z = 0 → C.ip vL.2 z = 0 → (∀ q b, (a ++ [false]) <+: q → C.ip (nz q b) z = 0) →
      C.ip d1.1 z = 0 ∧ C.ip d1.2 z = 0 := fun z => desc_orth sqrt C nz l vL p1 (a ++ [false]) z h1
  obtain ⟨o11, o21⟩ := stepL d2.1 ((C.symm _ _).trans r11) ((C.symm _ _).trans r12) (fun q b hq => by simpa using nzD true q b hq)
  obtain ⟨o12, o22⟩ := stepL d2.2 ((C.symm _ _).trans r21) ((C.symm _ _).trans r22) (fun q b hq => by simpa using nzD false q b hq)
  exact ⟨o11, o12, o21, o22⟩

theorem valueAt_append (o : Ops K R) : ∀ (t : Model.BM.Tree K) (top : R × R) (a p pre : Path) {va : R × R} {na : Model.BM.Tree K},
    valueAt o top t a pre = some va → t.get? a = some na → valueAt o top t (a ++ p) pre = valueAt o va na p (pre ++ a)
  | t, top, [], p, pre, va, na, hv, hg => by
      have e1 : va = top := by cases t <;> simpa [valueAt] using hv.symm
      have e2 : na = t := by cases t <;> simpa [Model.BM.Tree.get?] using hg.symm
      subst e1 e2; simp
  | Model.BM.Tree.leaf _ _, _, _ :: _, _, _, _, _, hv, _ => by simp [valueAt] at hv
  | Model.BM.Tree.node s e m l r, top, b :: a, p, pre, va, na, hv, hg => by
      simp only [valueAt, List.cons_append] at hv ⊢
      cases b
      · simp only [Model.BM.Tree.get?, Bool.false_eq_true, if_false] at hg
        simp only [Bool.false_eq_true, if_false] at hv ⊢
        rw [valueAt_append o l _ a p (pre ++ [false]) hv hg]; simp
      · simp only [Model.BM.Tree.get?, if_true] at hg
        simp only [if_true] at hv ⊢
        rw [valueAt_append o r _ a p (pre ++ [true]) hv hg]; simp

theorem get?_append : ∀ (t : Model.BM.Tree K) (a p : Path) {na : Model.BM.Tree K},
    t.get? a = some na → t.get? (a ++ p) = na.get? p
  | t, [], p, na, hg => by
      have e2 : na = t := by cases t <;> simpa [Model.BM.Tree.get?] using hg.symm
      subst e2; rfl
  | Model.BM.Tree.leaf _ _, _ :: _, _, _, hg => by simp [Model.BM.Tree.get?] at hg
  | Model.BM.Tree.node s e m l r, b :: a, p, na, hg => by
      cases b
      · simp only [Model.BM.Tree.get?, Bool.false_eq_true, if_false, List.cons_append] at hg ⊢
        exact get?_append l a p hg
      · simp only [Model.BM.Tree.get?, if_true, List.cons_append] at hg ⊢
        exact get?_append r a p hg

theorem wf_get : ∀ {t : Model.BM.Tree K} {a : Path} {na : Model.BM.Tree K}, WF c t → t.get? a = some na → WF c na
  | t, [], na, hw, hg => by
      have e2 : na = t := by cases t <;> simpa [Model.BM.Tree.get?] using hg.symm
      subst e2; exact hw
  | Model.BM.Tree.leaf _ _, _ :: _, _, _, hg => by simp [Model.BM.Tree.get?] at hg
  | Model.BM.Tree.node s e m l r, b :: a, na, hw, hg => by
      obtain ⟨_, _, _, _, _, _, _, hwl, hwr⟩ := hw
      cases b
      · simp only [Model.BM.Tree.get?, Bool.false_eq_true, if_false] at hg; exact wf_get hwl hg
      · simp only [Model.BM.Tree.get?, if_true] at hg; exact wf_get hwr hg

/-- **C04, independent increments, every tree.**  Two nodes of a well-formed tree whose paths diverge (one goes left where the other goes
right: their intervals are disjoint) have uncorrelated `(W, H)` - all four covariances vanish.  With `node_law`: the `(W, H)` of any
family of pairwise disjoint nodes have exactly the second moments of Brownian increments and space-time Levy areas. -/
theorem disjoint_law (hsq : ∀ x : K, 0 ≤ x → sqrt x * sqrt x = x) (hn : NoiseON C nz) {t : Model.BM.Tree K} (hwf : WF c t)
    {top : R × R} (hl : LawAt C top t.s t.e) (hf : Fresh C nz top []) {a p1 p2 : Path} {d1 d2 : R × R} {n1 n2 : Model.BM.Tree K}
    (h1 : valueAt (vecOps sqrt nz) top t (a ++ false :: p1) [] = some d1)
    (h2 : valueAt (vecOps sqrt nz) top t (a ++ true :: p2) [] = some d2)
    (g1 : t.get? (a ++ false :: p1) = some n1) (g2 : t.get? (a ++ true :: p2) = some n2) :
    C.ip d1.1 d2.1 = 0 ∧ C.ip d1.1 d2.2 = 0 ∧ C.ip d1.2 d2.1 = 0 ∧ C.ip d1.2 d2.2 = 0 := by
  -- the node at which the two paths part
  have hna : ∃ na, t.get? a = some na := by
    cases h : t.get? a with
    | some na => exact ⟨na, rfl⟩
    | none =>
      exfalso
      have : ∀ (t : Model.BM.Tree K) (a p : Path), t.get? a = none → t.get? (a ++ p) = none := by
        intro t a
        induction a generalizing t with
        | nil => intro p h; cases t <;> simp [Model.BM.Tree.get?] at h
        | cons b a ih =>
          intro p h
          cases t with
          | leaf _ _ => simp [Model.BM.Tree.get?]
          | node s e m l r =>
            cases b
            · simp only [Model.BM.Tree.get?, Bool.false_eq_true, if_false, List.cons_append] at h ⊢; exact ih l p h
            · simp only [Model.BM.Tree.get?, if_true, List.cons_append] at h ⊢; exact ih r p h
      rw [this t a _ h] at g1; simp at g1
  obtain ⟨na, hga⟩ := hna
  have hva : ∃ va, valueAt (vecOps sqrt nz) top t a [] = some va := by
    cases h : valueAt (vecOps sqrt nz) top t a [] with
    | some va => exact ⟨va, rfl⟩
    | none =>
      exfalso
      have : ∀ (t : Model.BM.Tree K) (top : R × R) (a p pre : Path), valueAt (vecOps sqrt nz) top t a pre = none →
          valueAt (vecOps sqrt nz) top t (a ++ p) pre = none := by
        intro t top a
        induction a generalizing t top with
        | nil => intro p pre h; cases t <;> simp [valueAt] at h
        | cons b a ih =>
          intro p pre h
          cases t with
          | leaf _ _ => simp [valueAt]
          | node s e m l r =>
            simp only [valueAt, List.cons_append] at h ⊢
            exact ih _ _ p _ h
      rw [this t top a _ [] h] at h1; simp at h1
  obtain ⟨va, hva⟩ := hva
  obtain ⟨lawA, freshA⟩ := node_law sqrt C nz hsq hn t top a [] hwf hl hf hva hga
  simp only [List.nil_append] at freshA
  rw [valueAt_append _ t top a _ [] hva hga] at h1 h2
  rw [get?_append t a _ hga] at g1 g2
  simp only [List.nil_append] at h1 h2
  have hwa := wf_get hwf hga
  cases na with
  | leaf _ _ => simp [Model.BM.Tree.get?] at g1
  | node s e m l r =>
    simp only [Model.BM.Tree.get?, Bool.false_eq_true, if_false, if_true] at g1 g2
    exact diverge_law sqrt C nz hsq hn hwa (by simpa [Model.BM.Tree.s, Model.BM.Tree.e] using lawA) freshA h1 h2 g1 g2

/-! ### the law of a query: `Var W(ta, tb) = tb - ta` for every resolved interval -/

/-- cross covariances of the two children of one split -/
theorem split_cross (hsq : ∀ x : K, 0 ≤ x → sqrt x * sqrt x = x) (hn : NoiseON C nz) {s m e : K} (hsm : s < m) (hme : m < e)
    {par : R × R} {pre : Path} (hl : LawAt C par s e) (hf : Fresh C nz par pre) :
    let vL := (vecOps sqrt nz).bridge s m e true par (nz pre false) (nz pre true)
    let vR := (vecOps sqrt nz).bridge s m e false par (nz pre false) (nz pre true)
    C.ip vL.1 vR.1 = 0 ∧ C.ip vL.1 vR.2 = 0 ∧ C.ip vL.2 vR.1 = 0 ∧ C.ip vL.2 vR.2 = 0 := by
  obtain ⟨hWW, hHH, hWH⟩ := hl
  have hself : ¬ StrictPrefix pre pre := by
    rintro ⟨u, hu, h⟩
    have : (pre ++ u).length = pre.length := by rw [h]
    simp at this; exact hu this
  obtain ⟨f1a, f1b⟩ := hf pre false hself
  obtain ⟨f2a, f2b⟩ := hf pre true hself
  have h12 : C.ip (nz pre false) (nz pre true) = 0 := hn.orth _ _ _ _ (by simp)
  have law := C04.split_law sqrt s (m - s) (e - m) (sub_pos.mpr hsm) (sub_pos.mpr hme) hsq
  simp only [show s + (m - s) = m by ring, show m + (e - m) = e by ring, show m - s + (e - m) = e - s by ring] at law
  obtain ⟨_, _, _, _, _, _, x1, x2, x3, x4⟩ := law
  have key := fun f g => ip_lin C f g par.1 par.2 (nz pre false) (nz pre true) (e - s) hWW hHH hWH (hn.unit _ _) (hn.unit _ _) h12
    f1a f2a f1b f2b
  intro vL vR
  simp only [vL, vR, vecOps, if_true, Bool.false_eq_true, if_false]
  exact ⟨(key _ _).trans x1, (key _ _).trans x2, (key _ _).trans x3, (key _ _).trans x4⟩

/-- the increment functional of C03Model, for vector-valued nodes -/
abbrev φV : R × R → K → K → R := fun v _ _ => v.1

/-- a vector uncorrelated with the `W` of every piece is uncorrelated with their sum -/
theorem sumW_orth (o : Ops K R) (top : R × R) (t : Model.BM.Tree K) (pre : Path) (z : R) : ∀ (ps : List Path) {X : R},
    C03Model.sumW o (φV (K := K)) top t pre ps = some X →
    (∀ p ∈ ps, ∀ (v : R × R) (nd : Model.BM.Tree K), valueAt o top t p pre = some v → t.get? p = some nd → C.ip v.1 z = 0) →
    C.ip X z = 0
  | [], X, h, _ => by
      simp only [C03Model.sumW, Option.some.injEq] at h
      subst h
      have := C.smul_left 0 (0 : R) z
      simpa using this
  | p :: ps, X, h, hp => by
      simp only [C03Model.sumW] at h
      split at h
      · rename_i v nd sx hv hg hs
        simp only [Option.some.injEq] at h
        subst h
        rw [C.add_left, hp p (by simp) v nd hv hg, sumW_orth o top t pre z ps hs (fun q hq => hp q (by simp [hq])), add_zero]
      · simp at h

/-- **C04, the increment of every resolved query.**  In any well-formed tree: the sum of the `W`-values of the pieces that `find` selects
for `[ta, tb]` (which is the `W` a query returns, `C03Model.answerSpec_W`) has variance exactly `tb - ta`. -/
theorem query_var (hsq : ∀ x : K, 0 ≤ x → sqrt x * sqrt x = x) (hn : NoiseON C nz) :
    ∀ (t : Model.BM.Tree K) (top : R × R) (pre : Path) (ta tb : K) {ps : List Path}, WF c t → LawAt C top t.s t.e →
      Fresh C nz top pre → find t ta tb = some ps →
      ∃ X, C03Model.sumW (vecOps sqrt nz) (φV (K := K)) top t pre ps = some X ∧ C.ip X X = tb - ta
  | Model.BM.Tree.leaf s e, top, pre, ta, tb, ps, _, hl, _, h => by
      simp only [find] at h
      split at h
      · rename_i hc
        simp only [Option.some.injEq] at h; subst h
        refine ⟨top.1, by simp [C03Model.sumW, valueAt, Model.BM.Tree.get?], ?_⟩
        rw [hc.1, hc.2]; exact hl.1
      · simp at h
  | Model.BM.Tree.node s e m l r, top, pre, ta, tb, ps, hwf, hl, hf, h => by
      obtain ⟨hsm, hme, _, hls, hle, hrs, hre, hwl, hwr⟩ := hwf
      simp only [Model.BM.Tree.s, Model.BM.Tree.e] at hl
      obtain ⟨lawL, freshL⟩ := child_law sqrt C nz hsq hn hsm hme hl hf true
      obtain ⟨lawR, freshR⟩ := child_law sqrt C nz hsq hn hsm hme hl hf false
      simp only [Bool.not_true, Bool.not_false, if_true, Bool.false_eq_true, if_false] at lawL freshL lawR freshR
      obtain ⟨c11, c12, c21, c22⟩ := split_cross sqrt C nz hsq hn hsm hme hl hf
      simp only [find] at h
      split at h
      · rename_i hc
        simp only [Option.some.injEq] at h; subst h
        refine ⟨top.1, by simp [C03Model.sumW, valueAt, Model.BM.Tree.get?], ?_⟩
        rw [hc.1, hc.2]; exact hl.1
      · split at h
        · cases hfl : find l ta tb with
          | none => simp [hfl] at h
          | some a =>
            simp only [hfl, Option.map_some, Option.some.injEq] at h; subst h
            obtain ⟨X, hX, hv⟩ := query_var hsq hn l _ (pre ++ [false]) ta tb hwl (by rw [hls, hle]; exact lawL) freshL hfl
            exact ⟨X, by rw [C03Model.sumW_child]; simp only [Bool.not_false, Bool.false_eq_true, if_false]; exact hX, hv⟩
        · split at h
          · cases hfr : find r ta tb with
            | none => simp [hfr] at h
            | some a =>
              simp only [hfr, Option.map_some, Option.some.injEq] at h; subst h
              obtain ⟨X, hX, hv⟩ := query_var hsq hn r _ (pre ++ [true]) ta tb hwr (by rw [hrs, hre]; exact lawR) freshR hfr
              exact ⟨X, by rw [C03Model.sumW_child]; simp only [Bool.not_true, if_true]; exact hX, hv⟩
          · cases hfl : find l ta m with
            | none => simp [hfl] at h
            | some a =>
              cases hfr : find r m tb with
              | none => simp [hfl, hfr] at h
              | some b =>
                simp only [hfl, hfr, Option.some.injEq] at h; subst h
                obtain ⟨XL, hXL, vL⟩ := query_var hsq hn l _ (pre ++ [false]) ta m hwl (by rw [hls, hle]; exact lawL) freshL hfl
                obtain ⟨XR, hXR, vR⟩ := query_var hsq hn r _ (pre ++ [true]) m tb hwr (by rw [hrs, hre]; exact lawR) freshR hfr
                set cL := (vecOps sqrt nz).bridge s m e true top (nz pre false) (nz pre true) with hcL
                set cR := (vecOps sqrt nz).bridge s m e false top (nz pre false) (nz pre true) with hcR
                -- the left sum is uncorrelated with the right child ...
                have lR : ∀ (i : Bool), C.ip XL (if i then cR.1 else cR.2) = 0 := by
                  intro i
                  apply sumW_orth C _ cL l (pre ++ [false]) _ a hXL
                  intro p _ v nd hv _
                  refine (desc_orth sqrt C nz l cL p (pre ++ [false]) _ hv ?_ ?_ ?_).1
                  · cases i
                    · simpa using c12
                    · simpa using c11
                  · cases i
                    · simpa using c22
                    · simpa using c21
                  · intro q b' hq
                    have := freshR q b' (by
                      have := not_strictPrefix_of_diverge (b := false) (r := []) hq
                      simpa using this)
                    rw [C.symm]
                    cases i
                    · simpa using this.2
                    · simpa using this.1
                -- ... and with all noise drawn at or below the right child
                have lN : ∀ q b', (pre ++ [true]) <+: q → C.ip XL (nz q b') = 0 := by
                  intro q b' hq
                  apply sumW_orth C _ cL l (pre ++ [false]) _ a hXL
                  intro p _ v nd hv hg
                  obtain ⟨_, fr⟩ := node_law sqrt C nz hsq hn l cL p (pre ++ [false]) hwl (by rw [hls, hle]; exact lawL) freshL hv hg
                  exact (fr q b' (by
                    have := not_strictPrefix_of_diverge (b := true) (r := p) hq
                    simpa using this)).1
                -- hence every piece on the right is uncorrelated with the left sum
                have cross : C.ip XR XL = 0 := by
                  apply sumW_orth C _ cR r (pre ++ [true]) _ b hXR
                  intro p _ v nd hv _
                  refine (desc_orth sqrt C nz r cR p (pre ++ [true]) XL hv ?_ ?_ ?_).1
                  · rw [C.symm]; simpa using lR true
                  · rw [C.symm]; simpa using lR false
                  · intro q b' hq; rw [C.symm]; exact lN q b' hq
                refine ⟨XL + XR, ?_, ?_⟩
                · apply C03Model.sumW_append
                  · rw [C03Model.sumW_child]; simp only [Bool.not_false, Bool.false_eq_true, if_false]; exact hXL
                  · rw [C03Model.sumW_child]; simp only [Bool.not_true, if_true]; exact hXR
                · rw [C.add_left, C.add_right, C.add_right, vL, vR, cross, (C.symm XL XR).trans cross]; ring

/-! ### the joint law of `(W, U)` of a query: arbitrary linear node functionals -/

/-- a node functional linear in `(W, H)` with coefficients depending on the node's interval -/
structure LinF (K : Type) where
  a : K → K → K
  b : K → K → K

/-- its value on a node -/
def LinF.app (ψ : LinF K) : R × R → K → K → R := fun v s e => ψ.a s e • v.1 + ψ.b s e • v.2

theorem sumF_orth (o : Ops K R) (ψ : LinF K) (top : R × R) (t : Model.BM.Tree K) (pre : Path) (z : R) : ∀ (ps : List Path) {X : R},
    C03Model.sumW o (ψ.app (R := R)) top t pre ps = some X →
    (∀ p ∈ ps, ∀ (v : R × R) (nd : Model.BM.Tree K), valueAt o top t p pre = some v → t.get? p = some nd →
      C.ip v.1 z = 0 ∧ C.ip v.2 z = 0) →
    C.ip X z = 0
  | [], X, h, _ => by
      simp only [C03Model.sumW, Option.some.injEq] at h
      subst h
      have := C.smul_left 0 (0 : R) z
      simpa using this
  | p :: ps, X, h, hp => by
      simp only [C03Model.sumW] at h
      split at h
      · rename_i v nd sx hv hg hs
        simp only [Option.some.injEq] at h
        subst h
        obtain ⟨o1, o2⟩ := hp p (by simp) v nd hv hg
        rw [C.add_left, sumF_orth o ψ top t pre z ps hs (fun q hq => hp q (by simp [hq]))]
        simp only [LinF.app, C.add_left, C.smul_left, o1, o2]; ring
      · simp at h

/-- any functional summed over pieces of the left subtree is uncorrelated with any functional summed over pieces of the right subtree -/
theorem straddle_cross (hsq : ∀ x : K, 0 ≤ x → sqrt x * sqrt x = x) (hn : NoiseON C nz) {s m e : K} {l r : Model.BM.Tree K}
    (hwf : WF c (Model.BM.Tree.node s e m l r)) {top : R × R} {pre : Path} (hl : LawAt C top s e) (hf : Fresh C nz top pre)
    (ψ ψ' : LinF K) {a b : List Path} {XL XR : R}
    (hXL : C03Model.sumW (vecOps sqrt nz) (ψ.app (R := R)) ((vecOps sqrt nz).bridge s m e true top (nz pre false) (nz pre true)) l
      (pre ++ [false]) a = some XL)
    (hXR : C03Model.sumW (vecOps sqrt nz) (ψ'.app (R := R)) ((vecOps sqrt nz).bridge s m e false top (nz pre false) (nz pre true)) r
      (pre ++ [true]) b = some XR) : C.ip XL XR = 0 := by
  obtain ⟨hsm, hme, _, hls, hle, hrs, hre, hwl, hwr⟩ := hwf
  obtain ⟨lawL, freshL⟩ := child_law sqrt C nz hsq hn hsm hme hl hf true
  obtain ⟨lawR, freshR⟩ := child_law sqrt C nz hsq hn hsm hme hl hf false
  simp only [Bool.not_true, Bool.not_false, if_true, Bool.false_eq_true, if_false] at lawL freshL lawR freshR
  obtain ⟨c11, c12, c21, c22⟩ := split_cross sqrt C nz hsq hn hsm hme hl hf
  set cL := (vecOps sqrt nz).bridge s m e true top (nz pre false) (nz pre true) with hcL
  set cR := (vecOps sqrt nz).bridge s m e false top (nz pre false) (nz pre true) with hcR
  have lR : ∀ (i : Bool), C.ip XL (if i then cR.1 else cR.2) = 0 := by
    intro i
    apply sumF_orth C _ ψ cL l (pre ++ [false]) _ a hXL
    intro p _ v nd hv _
    refine desc_orth sqrt C nz l cL p (pre ++ [false]) _ hv ?_ ?_ ?_
    · cases i
      · simpa using c12
      · simpa using c11
    · cases i
      · simpa using c22
      · simpa using c21
    · intro q b' hq
      have := freshR q b' (by
        have := not_strictPrefix_of_diverge (b := false) (r := []) hq
        simpa using this)
      rw [C.symm]
      cases i
      · simpa using this.2
      · simpa using this.1
  have lN : ∀ q b', (pre ++ [true]) <+: q → C.ip XL (nz q b') = 0 := by
    intro q b' hq
    apply sumF_orth C _ ψ cL l (pre ++ [false]) _ a hXL
    intro p _ v nd hv hg
    obtain ⟨_, fr⟩ := node_law sqrt C nz hsq hn l cL p (pre ++ [false]) hwl (by rw [hls, hle]; exact lawL) freshL hv hg
    exact fr q b' (by
      have := not_strictPrefix_of_diverge (b := true) (r := p) hq
      simpa using this)
  rw [C.symm]
  apply sumF_orth C _ ψ' cR r (pre ++ [true]) _ b hXR
  intro p _ v nd hv _
  refine desc_orth sqrt C nz r cR p (pre ++ [true]) XL hv ?_ ?_ ?_
  · rw [C.symm]; simpa using lR true
  · rw [C.symm]; simpa using lR false
  · intro q b' hq; rw [C.symm]; exact lN q b' hq

/-- **C04, the second moments of every resolved query.**  For two linear node functionals whose covariance on a single node `[s,e]` of
Brownian law telescopes (`= G s - G e`), the covariance of their sums over the pieces `find` selects for `[ta, tb]` is `G ta - G tb`,
in any well-formed tree.  Instances below: `Var W = h`, `Cov(W, U) = h²/2`, `Var U = h³/3` with `h = tb - ta`. -/
theorem query_cov (hsq : ∀ x : K, 0 ≤ x → sqrt x * sqrt x = x) (hn : NoiseON C nz) (ψ1 ψ2 : LinF K) (G : K → K)
    (hG : ∀ s e, s < e → ψ1.a s e * ψ2.a s e * (e - s) + ψ1.b s e * ψ2.b s e * ((e - s) / 12) = G s - G e) :
    ∀ (t : Model.BM.Tree K) (top : R × R) (pre : Path) (ta tb : K) {ps : List Path}, WF c t → LawAt C top t.s t.e →
      Fresh C nz top pre → find t ta tb = some ps →
      ∃ X1 X2, C03Model.sumW (vecOps sqrt nz) (ψ1.app (R := R)) top t pre ps = some X1 ∧
        C03Model.sumW (vecOps sqrt nz) (ψ2.app (R := R)) top t pre ps = some X2 ∧ C.ip X1 X2 = G ta - G tb
  | Model.BM.Tree.leaf s e, top, pre, ta, tb, ps, hwf, hl, _, h => by
      simp only [find] at h
      split at h
      · rename_i hc
        simp only [Option.some.injEq] at h; subst h
        refine ⟨_, _, by simp [C03Model.sumW, valueAt, Model.BM.Tree.get?]; rfl, by simp [C03Model.sumW, valueAt, Model.BM.Tree.get?]; rfl, ?_⟩
        obtain ⟨w1, w2, w3⟩ := hl
        simp only [Model.BM.Tree.s, Model.BM.Tree.e] at w1 w2 w3 ⊢
        simp only [LinF.app, C.add_left, C.add_right, C.smul_left, C.smul_right, w1, w2, w3, (C.symm top.2 top.1).trans w3]
        rw [hc.1, hc.2, ← hG s e hwf.1]; ring
      · simp at h
  | Model.BM.Tree.node s e m l r, top, pre, ta, tb, ps, hwf, hl, hf, h => by
      have hwf' := hwf
      obtain ⟨hsm, hme, _, hls, hle, hrs, hre, hwl, hwr⟩ := hwf
      simp only [Model.BM.Tree.s, Model.BM.Tree.e] at hl
      obtain ⟨lawL, freshL⟩ := child_law sqrt C nz hsq hn hsm hme hl hf true
      obtain ⟨lawR, freshR⟩ := child_law sqrt C nz hsq hn hsm hme hl hf false
      simp only [Bool.not_true, Bool.not_false, if_true, Bool.false_eq_true, if_false] at lawL freshL lawR freshR
      simp only [find] at h
      split at h
      · rename_i hc
        simp only [Option.some.injEq] at h; subst h
        refine ⟨_, _, by simp [C03Model.sumW, valueAt, Model.BM.Tree.get?]; rfl, by simp [C03Model.sumW, valueAt, Model.BM.Tree.get?]; rfl, ?_⟩
        obtain ⟨w1, w2, w3⟩ := hl
        simp only [Model.BM.Tree.s, Model.BM.Tree.e]
        simp only [LinF.app, C.add_left, C.add_right, C.smul_left, C.smul_right, w1, w2, w3, (C.symm top.2 top.1).trans w3]
        rw [hc.1, hc.2, ← hG s e (lt_trans hsm hme)]; ring
      · split at h
        · cases hfl : find l ta tb with
          | none => simp [hfl] at h
          | some a =>
            simp only [hfl, Option.map_some, Option.some.injEq] at h; subst h
            obtain ⟨X1, X2, h1, h2, hv⟩ := query_cov hsq hn ψ1 ψ2 G hG l _ (pre ++ [false]) ta tb hwl (by rw [hls, hle]; exact lawL) freshL hfl
            exact ⟨X1, X2, by rw [C03Model.sumW_child]; simp only [Bool.not_false, Bool.false_eq_true, if_false]; exact h1,
              by rw [C03Model.sumW_child]; simp only [Bool.not_false, Bool.false_eq_true, if_false]; exact h2, hv⟩
        · split at h
          · cases hfr : find r ta tb with
            | none => simp [hfr] at h
            | some a =>
              simp only [hfr, Option.map_some, Option.some.injEq] at h; subst h
              obtain ⟨X1, X2, h1, h2, hv⟩ := query_cov hsq hn ψ1 ψ2 G hG r _ (pre ++ [true]) ta tb hwr (by rw [hrs, hre]; exact lawR) freshR hfr
              exact ⟨X1, X2, by rw [C03Model.sumW_child]; simp only [Bool.not_true, if_true]; exact h1,
                by rw [C03Model.sumW_child]; simp only [Bool.not_true, if_true]; exact h2, hv⟩
          · cases hfl : find l ta m with
            | none => simp [hfl] at h
            | some a =>
              cases hfr : find r m tb with
              | none => simp [hfl, hfr] at h
              | some b =>
                simp only [hfl, hfr, Option.some.injEq] at h; subst h
                obtain ⟨L1, L2, hL1, hL2, vL⟩ := query_cov hsq hn ψ1 ψ2 G hG l _ (pre ++ [false]) ta m hwl (by rw [hls, hle]; exact lawL) freshL hfl
                obtain ⟨R1, R2, hR1, hR2, vR⟩ := query_cov hsq hn ψ1 ψ2 G hG r _ (pre ++ [true]) m tb hwr (by rw [hrs, hre]; exact lawR) freshR hfr
                have x12 := straddle_cross sqrt C nz hsq hn hwf' hl hf ψ1 ψ2 hL1 hR2
                have x21 := straddle_cross sqrt C nz hsq hn hwf' hl hf ψ2 ψ1 hL2 hR1
                refine ⟨L1 + R1, L2 + R2, ?_, ?_, ?_⟩
                · apply C03Model.sumW_append
                  · rw [C03Model.sumW_child]; simp only [Bool.not_false, Bool.false_eq_true, if_false]; exact hL1
                  · rw [C03Model.sumW_child]; simp only [Bool.not_true, if_true]; exact hR1
                · apply C03Model.sumW_append
                  · rw [C03Model.sumW_child]; simp only [Bool.not_false, Bool.false_eq_true, if_false]; exact hL2
                  · rw [C03Model.sumW_child]; simp only [Bool.not_true, if_true]; exact hR2
                · rw [C.add_left, C.add_right, C.add_right, vL, vR, x12, (C.symm R1 L2).trans x21]; ring

/-- the increment `W` of a node -/
def ψW : LinF K := ⟨fun _ _ => 1, fun _ _ => 0⟩
/-- the Chen weight `U + (tb - e) W = (e - s)(W/2 + H) + (tb - e) W` of a node relative to the right end point `tb` of the query
(`C03Model.φU`: summed over the pieces it is the `U` the query returns) -/
def ψU (tb : K) : LinF K := ⟨fun s e => (e - s) / 2 + (tb - e), fun s e => e - s⟩

/-- `Var W(ta,tb) = tb - ta`, `Cov(W, U)(ta,tb) = (tb - ta)²/2`, `Var U(ta,tb) = (tb - ta)³/3` for every resolved query of every tree -/
theorem query_WU (hsq : ∀ x : K, 0 ≤ x → sqrt x * sqrt x = x) (hn : NoiseON C nz) (t : Model.BM.Tree K) (top : R × R) (pre : Path)
    (ta tb : K) {ps : List Path} (hwf : WF c t) (hl : LawAt C top t.s t.e) (hf : Fresh C nz top pre) (h : find t ta tb = some ps) :
    ∃ W U, C03Model.sumW (vecOps sqrt nz) ((ψW (K := K)).app (R := R)) top t pre ps = some W ∧
      C03Model.sumW (vecOps sqrt nz) ((ψU tb).app (R := R)) top t pre ps = some U ∧
      C.ip W W = tb - ta ∧ C.ip W U = (tb - ta) ^ 2 / 2 ∧ C.ip U U = (tb - ta) ^ 3 / 3 := by
  obtain ⟨W, W', h1, h1', vWW⟩ := query_cov sqrt C nz hsq hn ψW ψW (fun x => -x) (by intro s e _; simp only [ψW]; ring) t top pre ta tb hwf hl hf h
  obtain ⟨W2, U, h2, h3, vWU⟩ := query_cov sqrt C nz hsq hn ψW (ψU tb) (fun x => (tb - x) ^ 2 / 2)
    (by intro s e _; simp only [ψW, ψU]; ring) t top pre ta tb hwf hl hf h
  obtain ⟨U2, U3, h4, h5, vUU⟩ := query_cov sqrt C nz hsq hn (ψU tb) (ψU tb) (fun x => (tb - x) ^ 3 / 3)
    (by intro s e _; simp only [ψU]; ring) t top pre ta tb hwf hl hf h
  have e1 : W' = W := Option.some.inj (h1'.symm.trans h1)
  have e2 : W2 = W := Option.some.inj (h2.symm.trans h1)
  have e3 : U2 = U := Option.some.inj (h4.symm.trans h3)
  have e4 : U3 = U := Option.some.inj (h5.symm.trans h3)
  rw [e1] at vWW
  rw [e2] at vWU
  rw [e3, e4] at vUU
  refine ⟨W, U, h1, h3, ?_, ?_, ?_⟩
  · rw [vWW]; ring
  · rw [vWU]; ring
  · rw [vUU]; ring

/-! ### independent increments at the level of queries -/

theorem get_bounds : ∀ {t : Model.BM.Tree K} {p : Path} {nd : Model.BM.Tree K}, WF c t → t.get? p = some nd → t.s ≤ nd.s ∧ nd.e ≤ t.e
  | t, [], nd, _, hg => by
      have e2 : nd = t := by cases t <;> simpa [Model.BM.Tree.get?] using hg.symm
      subst e2; exact ⟨le_refl _, le_refl _⟩
  | Model.BM.Tree.leaf _ _, _ :: _, _, _, hg => by simp [Model.BM.Tree.get?] at hg
  | Model.BM.Tree.node s e m l r, b :: p, nd, hw, hg => by
      obtain ⟨hsm, hme, _, hls, hle, hrs, hre, hwl, hwr⟩ := hw
      simp only [Model.BM.Tree.s, Model.BM.Tree.e]
      cases b
      · simp only [Model.BM.Tree.get?, Bool.false_eq_true, if_false] at hg
        obtain ⟨h1, h2⟩ := get_bounds hwl hg
        exact ⟨by rw [← hls]; exact h1, le_trans h2 (by rw [hle]; exact le_of_lt hme)⟩
      · simp only [Model.BM.Tree.get?, if_true] at hg
        obtain ⟨h1, h2⟩ := get_bounds hwr hg
        exact ⟨le_trans (by rw [hrs]; exact le_of_lt hsm) h1, by rw [← hre]; exact h2⟩

theorem chain_le {t : Model.BM.Tree K} : ∀ {ps : List Path} {a b : K}, C03Model.chainP t a b ps → a ≤ b
  | [], a, b, h => by simp only [C03Model.chainP] at h; exact le_of_eq h
  | p :: ps, a, b, h => by
      obtain ⟨nd, _, hs, hlt, hr⟩ := h
      exact le_trans (by rw [← hs]; exact le_of_lt hlt) (chain_le hr)

/-- every piece of a chain from `a` to `b` is a non-degenerate node inside `[a, b]` -/
theorem chain_mem {t : Model.BM.Tree K} : ∀ {ps : List Path} {a b : K}, C03Model.chainP t a b ps → ∀ p ∈ ps,
    ∃ nd, t.get? p = some nd ∧ a ≤ nd.s ∧ nd.e ≤ b ∧ nd.s < nd.e
  | [], _, _, _, p, hp => by simp at hp
  | q :: ps, a, b, h, p, hp => by
      obtain ⟨nd, hg, hs, hlt, hr⟩ := h
      rcases List.mem_cons.mp hp with rfl | hp'
      · exact ⟨nd, hg, le_of_eq hs.symm, chain_le hr, hlt⟩
      · obtain ⟨nd', hg', h1, h2, h3⟩ := chain_mem hr p hp'
        exact ⟨nd', hg', le_trans (by rw [← hs]; exact le_of_lt hlt) h1, h2, h3⟩

theorem path_trichotomy : ∀ (p1 p2 : Path), p1 <+: p2 ∨ p2 <+: p1 ∨
    ∃ (a r1 r2 : Path) (b : Bool), p1 = a ++ b :: r1 ∧ p2 = a ++ (!b) :: r2
  | [], p2 => Or.inl (List.nil_prefix)
  | _ :: _, [] => Or.inr (Or.inl List.nil_prefix)
  | b1 :: p1, b2 :: p2 => by
      by_cases hb : b1 = b2
      · subst hb
        rcases path_trichotomy p1 p2 with h | h | ⟨a, r1, r2, b, e1, e2⟩
        · exact Or.inl (by simpa using h)
        · exact Or.inr (Or.inl (by simpa using h))
        · exact Or.inr (Or.inr ⟨b1 :: a, r1, r2, b, by simp [e1], by simp [e2]⟩)
      · refine Or.inr (Or.inr ⟨[], p1, p2, b1, by simp, ?_⟩)
        have : b2 = !b1 := by cases b1 <;> cases b2 <;> simp_all
        simp [this]

/-- nodes whose paths diverge (left, right) are ordered in time -/
theorem diverge_order {t : Model.BM.Tree K} (hwf : WF c t) {a r1 r2 : Path} {n1 n2 : Model.BM.Tree K}
    (g1 : t.get? (a ++ false :: r1) = some n1) (g2 : t.get? (a ++ true :: r2) = some n2) : n1.e ≤ n2.s := by
  cases hga : t.get? a with
  | none =>
    exfalso
    have : ∀ (t : Model.BM.Tree K) (a p : Path), t.get? a = none → t.get? (a ++ p) = none := by
      intro t a
      induction a generalizing t with
      | nil => intro p h; cases t <;> simp [Model.BM.Tree.get?] at h
      | cons b a ih =>
        intro p h
        cases t with
        | leaf _ _ => simp [Model.BM.Tree.get?]
        | node s e m l r =>
          cases b
          · simp only [Model.BM.Tree.get?, Bool.false_eq_true, if_false, List.cons_append] at h ⊢; exact ih l p h
          · simp only [Model.BM.Tree.get?, if_true, List.cons_append] at h ⊢; exact ih r p h
    rw [this t a _ hga] at g1; simp at g1
  | some na =>
    rw [get?_append t a _ hga] at g1 g2
    have hwa := wf_get hwf hga
    cases na with
    | leaf _ _ => simp [Model.BM.Tree.get?] at g1
    | node s e m l r =>
      obtain ⟨_, _, _, _, hle, hrs, _, hwl, hwr⟩ := hwa
      simp only [Model.BM.Tree.get?, Bool.false_eq_true, if_false, if_true] at g1 g2
      have b1 := (get_bounds hwl g1).2
      have b2 := (get_bounds hwr g2).1
      rw [hle] at b1; rw [hrs] at b2
      exact le_trans b1 b2

/-- **C04, independent increments of queries.**  Two resolved queries `[ta, tb]` and `[tc, td]` with `tb ≤ tc` of one tree: any linear
functionals of their pieces (in particular their `W` and their `U`) are uncorrelated. -/
theorem queries_uncorrelated (hsq : ∀ x : K, 0 ≤ x → sqrt x * sqrt x = x) (hn : NoiseON C nz) {t : Model.BM.Tree K} (hwf : WF c t)
    {top : R × R} (hl : LawAt C top t.s t.e) (hf : Fresh C nz top []) (ψ1 ψ2 : LinF K) {ta tb tc td : K} (hord : tb ≤ tc)
    {ps1 ps2 : List Path} (f1 : find t ta tb = some ps1) (f2 : find t tc td = some ps2) {X1 X2 : R}
    (h1 : C03Model.sumW (vecOps sqrt nz) (ψ1.app (R := R)) top t [] ps1 = some X1)
    (h2 : C03Model.sumW (vecOps sqrt nz) (ψ2.app (R := R)) top t [] ps2 = some X2) : C.ip X1 X2 = 0 := by
  have ch1 := C03Model.find_chain hwf f1
  have ch2 := C03Model.find_chain hwf f2
  apply sumF_orth C _ ψ1 top t [] X2 ps1 h1
  intro p1 hp1 v1 n1 hv1 hg1
  obtain ⟨n1', hg1', a1, a2, a3⟩ := chain_mem ch1 p1 hp1
  have en1 : n1' = n1 := Option.some.inj (hg1'.symm.trans hg1)
  subst en1
  -- every piece of the second query is uncorrelated with this piece of the first
  have key : ∀ p2 ∈ ps2, ∀ (v2 : R × R) (n2 : Model.BM.Tree K), valueAt (vecOps sqrt nz) top t p2 [] = some v2 → t.get? p2 = some n2 →
      C.ip v1.1 v2.1 = 0 ∧ C.ip v1.1 v2.2 = 0 ∧ C.ip v1.2 v2.1 = 0 ∧ C.ip v1.2 v2.2 = 0 := by
    intro p2 hp2 v2 n2 hv2 hg2
    obtain ⟨n2', hg2', b1, b2, b3⟩ := chain_mem ch2 p2 hp2
    have en2 : n2' = n2 := Option.some.inj (hg2'.symm.trans hg2)
    subst en2
    rcases path_trichotomy p1 p2 with ⟨r, rfl⟩ | ⟨r, rfl⟩ | ⟨a, r1, r2, b, rfl, rfl⟩
    · -- p2 below p1: nested intervals, impossible
      exfalso
      rw [get?_append t p1 r hg1] at hg2
      obtain ⟨c1, c2⟩ := get_bounds (wf_get hwf hg1) hg2
      have : n2'.e ≤ n2'.s := le_trans c2 (le_trans a2 (le_trans hord b1))
      exact absurd b3 (not_lt.mpr this)
    · exfalso
      rw [get?_append t p2 r hg2] at hg1
      obtain ⟨c1, c2⟩ := get_bounds (wf_get hwf hg2) hg1
      have : n1'.e ≤ n1'.s := le_trans a2 (le_trans hord (le_trans b1 c1))
      exact absurd a3 (not_lt.mpr this)
    · cases b
      · exact disjoint_law sqrt C nz hsq hn hwf hl hf hv1 hv2 hg1 hg2
      · -- the first query's piece to the right of the second's: contradicts the order
        exfalso
        have := diverge_order hwf (a := a) (r1 := r2) (r2 := r1) (by simpa using hg2) (by simpa using hg1)
        have : n1'.e ≤ n1'.s := le_trans a2 (le_trans hord (le_trans b1 (le_trans (le_of_lt b3) this)))
        exact absurd a3 (not_lt.mpr this)
  constructor
  · rw [C.symm]
    apply sumF_orth C _ ψ2 top t [] v1.1 ps2 h2
    intro p2 hp2 v2 n2 hv2 hg2
    obtain ⟨k1, k2, _, _⟩ := key p2 hp2 v2 n2 hv2 hg2
    exact ⟨(C.symm _ _).trans k1, (C.symm _ _).trans k2⟩
  · rw [C.symm]
    apply sumF_orth C _ ψ2 top t [] v1.2 ps2 h2
    intro p2 hp2 v2 n2 hv2 hg2
    obtain ⟨_, _, k3, k4⟩ := key p2 hp2 v2 n2 hv2 hg2
    exact ⟨(C.symm _ _).trans k3, (C.symm _ _).trans k4⟩

/-! ### the covariance of two overlapping increments is the length of the overlap -/

/-- the vector-valued split is additive in `W` (the regenerated kernels are: `C03.split_add_H` at the four unit vectors) -/
theorem vecOps_splitAdditive : C03Model.SplitAdditive (vecOps sqrt nz) (φV (K := K) (R := R)) := by
  intro s m e par x1 x2 hsm hme
  have h : e - s ≠ 0 := ne_of_gt (sub_pos.mpr (lt_trans hsm hme))
  have a1 := C03.split_add_H sqrt s m e 1 0 0 0 h
  have a2 := C03.split_add_H sqrt s m e 0 1 0 0 h
  have a3 := C03.split_add_H sqrt s m e 0 0 1 0 h
  have a4 := C03.split_add_H sqrt s m e 0 0 0 1 h
  simp only [vecOps, if_true, Bool.false_eq_true, if_false, lin, coefs, φV]
  refine Eq.trans (b := (Gen.split_HL_W sqrt s m e 1 0 0 0 + Gen.split_HR_W sqrt s m e 1 0 0 0) • par.1
          + (Gen.split_HL_W sqrt s m e 0 1 0 0 + Gen.split_HR_W sqrt s m e 0 1 0 0) • par.2
          + (Gen.split_HL_W sqrt s m e 0 0 1 0 + Gen.split_HR_W sqrt s m e 0 0 1 0) • x1
          + (Gen.split_HL_W sqrt s m e 0 0 0 1 + Gen.split_HR_W sqrt s m e 0 0 0 1) • x2) ?_ ?_
  · simp only [add_smul]; abel
  · rw [a1, a2, a3, a4]; simp

/-- **C04 + C03: the covariance structure of Brownian increments.**  For resolved times `s < u < t' < v` of one tree (all five
intervals resolved): `Cov(W(s,t'), W(u,v)) = t' - u`, the length of the overlap.  (Additivity of the sums: `C03Model.find_additive`;
variance: `query_var`; independence of the disjoint parts: `queries_uncorrelated`.) -/
theorem overlap_cov (hsq : ∀ x : K, 0 ≤ x → sqrt x * sqrt x = x) (hn : NoiseON C nz) {t : Model.BM.Tree K} (hwf : WF c t)
    {top : R × R} (hl : LawAt C top t.s t.e) (hf : Fresh C nz top []) {s u t' v : K} (hsu : s < u) (hut : u < t') (htv : t' < v)
    {p1 p2 pa pb pc : List Path} (f1 : find t s t' = some p1) (f2 : find t u v = some p2)
    (fa : find t s u = some pa) (fb : find t u t' = some pb) (fc : find t t' v = some pc) :
    ∃ X1 X2, C03Model.sumW (vecOps sqrt nz) (φV (K := K)) top t [] p1 = some X1 ∧
      C03Model.sumW (vecOps sqrt nz) (φV (K := K)) top t [] p2 = some X2 ∧ C.ip X1 X2 = t' - u := by
  obtain ⟨xa, xb, ha, hb, h1⟩ := C03Model.find_additive (c := c) (vecOps_splitAdditive sqrt nz) t top [] s u t' hwf hsu hut f1 fa fb
  obtain ⟨xb', xc, hb', hc, h2⟩ := C03Model.find_additive (c := c) (vecOps_splitAdditive sqrt nz) t top [] u t' v hwf hut htv f2 fb fc
  have eb : xb' = xb := Option.some.inj (hb'.symm.trans hb)
  subst eb
  refine ⟨_, _, h1, h2, ?_⟩
  obtain ⟨xb2, hb2, vb⟩ := query_var sqrt C nz hsq hn t top [] u t' hwf hl hf fb
  have eb2 : xb2 = xb' := Option.some.inj (hb2.symm.trans hb)
  subst eb2
  -- sums of `φV` are sums of `ψW.app`
  have conv : ∀ (ps : List Path) {X : R}, C03Model.sumW (vecOps sqrt nz) (φV (K := K)) top t [] ps = some X →
      C03Model.sumW (vecOps sqrt nz) ((ψW (K := K)).app (R := R)) top t [] ps = some X := by
    intro ps
    induction ps with
    | nil => intro X h; simpa [C03Model.sumW] using h
    | cons p ps ih =>
      intro X h
      simp only [C03Model.sumW] at h ⊢
      split at h
      · rename_i v nd sx hv hg hs
        rw [hv, hg, ih hs]
        simp only [Option.some.injEq] at h ⊢
        rw [← h]; simp [LinF.app, ψW]
      · simp at h
  have oab := queries_uncorrelated sqrt C nz hsq hn hwf hl hf ψW ψW (le_refl u) fa fb (conv _ ha) (conv _ hb)
  have oac := queries_uncorrelated sqrt C nz hsq hn hwf hl hf ψW ψW (le_of_lt hut) fa fc (conv _ ha) (conv _ hc)
  have obc := queries_uncorrelated sqrt C nz hsq hn hwf hl hf ψW ψW (le_refl t') fb fc (conv _ hb) (conv _ hc)
  rw [C.add_left, C.add_right, C.add_right, oab, oac, vb, obc]; ring

/-- the root of a freshly constructed object: `W = sqrt(T)·ξ₀`, `H = sqrt(T/12)·ξ₁` with `ξ₀, ξ₁` standard, uncorrelated with each
other and with all node noise -/
theorem root_law (hsq : ∀ x : K, 0 ≤ x → sqrt x * sqrt x = x) {xi0 xi1 : R} {T : K} (hT : 0 ≤ T)
    (h00 : C.ip xi0 xi0 = 1) (h11 : C.ip xi1 xi1 = 1) (h01 : C.ip xi0 xi1 = 0)
    (h0n : ∀ q b, C.ip xi0 (nz q b) = 0) (h1n : ∀ q b, C.ip xi1 (nz q b) = 0) (s e : K) (hse : e - s = T) :
    LawAt C (sqrt T • xi0, sqrt (T / 12) • xi1) s e ∧ Fresh C nz (sqrt T • xi0, sqrt (T / 12) • xi1) [] := by
  refine ⟨⟨?_, ?_, ?_⟩, fun q b _ => ⟨?_, ?_⟩⟩
  · simp only [C.smul_left, C.smul_right, h00, hse]; rw [mul_one, hsq T hT]
  · simp only [C.smul_left, C.smul_right, h11, hse]; rw [mul_one, hsq (T / 12) (by positivity)]
  · simp only [C.smul_left, C.smul_right, h01]; ring
  · simp only [C.smul_left, h0n]; ring
  · simp only [C.smul_left, h1n]; ring

/-- **tie of the root to the regenerated constructor**: on coefficient vectors the root value assumed by `root_law` is what the traced
`BrownianInterval.__init__` computes from its two noise draws, coordinate by coordinate (`T = t1 - t0`). -/
theorem root_coordinatewise {ι : Type} (xi0 xi1 : ι → K) (t0 t1 : K) (i : ι) :
    (sqrt (t1 - t0) • xi0) i = Gen.root_init_W sqrt t0 t1 (xi0 i) (xi1 i) ∧
    (sqrt ((t1 - t0) / 12) • xi1) i = Gen.root_init_H sqrt t0 t1 (xi0 i) (xi1 i) := by
  simp [Gen.root_init_W, Gen.root_init_H, mul_comm]

end C04Model
