/-
C05 — repeated queries return identical values whatever happened in between.

Model: `Model/Brownian.lean` (tied to the real BrownianInterval after every query by vlib/corr_bm.py).
Values live in an ABSTRACT type with abstract operations (`Ops`): no law of arithmetic is used, so "equal" is equality of
the computed values under every interpretation of `+ × ÷ √ randn` — in particular bit-identical IEEE results.
Non-dyadic mode (`halfway_tree = False`), arbitrary cache size, `dt` hint given or inferred, any history.
-/
import Tsv.Proofs.BMCore
import Tsv.Proofs.BMCache

namespace C05
open Model.BM BMCore

variable {T V : Type} [LinearOrder T] {c : Cfg T} (o : Ops T V)

/-! ### values are functions of the path -/

theorem valueAt_refines : ∀ {t t' : Tree T} {p pre : Path} {top v : V × V}, Refines t t' →
    valueAt o top t p pre = some v → valueAt o top t' p pre = some v
  | t, t', [], pre, top, v, _, h => by cases t <;> cases t' <;> simpa [valueAt] using h
  | Tree.leaf _ _, _, _ :: _, _, _, _, _, h => by simp [valueAt] at h
  | Tree.node _ _ _ _ _, Tree.leaf _ _, _ :: _, _, _, _, hr, _ => hr.elim
  | Tree.node s e m l r, Tree.node s' e' m' l' r', b :: p, pre, top, v, hr, h => by
      obtain ⟨rfl, rfl, rfl, hl, hrr⟩ := hr
      simp only [valueAt] at h ⊢
      cases b
      · exact valueAt_refines hl h
      · exact valueAt_refines hrr h

theorem get_refines : ∀ {t t' : Tree T} {p : Path} {n : Tree T}, Refines t t' → t.get? p = some n →
    ∃ n', t'.get? p = some n' ∧ Refines n n'
  | t, t', [], n, hr, h => by
      simp only [Tree.get?, Option.some.injEq] at h; subst h; exact ⟨t', by simp [Tree.get?], hr⟩
  | Tree.leaf _ _, _, _ :: _, _, _, h => by simp [Tree.get?] at h
  | Tree.node _ _ _ _ _, Tree.leaf _ _, _ :: _, _, hr, _ => hr.elim
  | Tree.node s e m l r, Tree.node s' e' m' l' r', b :: p, n, hr, h => by
      obtain ⟨rfl, rfl, rfl, hl, hrr⟩ := hr
      simp only [Tree.get?] at h ⊢
      cases b
      · simpa using get_refines hl (by simpa using h)
      · simpa using get_refines hrr (by simpa using h)

theorem get_append : ∀ (t : Tree T) (q r : Path),
    t.get? (q ++ r) = match t.get? q with | some sub => sub.get? r | none => none
  | t, [], r => by simp [Tree.get?]
  | Tree.leaf _ _, b :: q, r => by simp [Tree.get?]
  | Tree.node s e m l r', b :: q, r => by
      simp only [List.cons_append, Tree.get?]
      cases b
      · simpa using get_append l q r
      · simpa using get_append r' q r

/-- the value at `q ++ r` is the value at `r` inside the subtree at `q`, started from the value at `q` -/
theorem valueAt_append : ∀ (t : Tree T) (q r pre : Path) (top : V × V),
    valueAt o top t (q ++ r) pre =
      match t.get? q, valueAt o top t q pre with
      | some sub, some v => valueAt o v sub r (pre ++ q)
      | _, _ => none
  | t, [], r, pre, top => by cases t <;> simp [Tree.get?, valueAt]
  | Tree.leaf _ _, b :: q, r, pre, top => by simp [Tree.get?, valueAt]
  | Tree.node s e m l r', b :: q, r, pre, top => by
      simp only [List.cons_append, valueAt, Tree.get?]
      cases b
      · simpa [List.append_assoc] using valueAt_append l q r (pre ++ [false]) _
      · simpa [List.append_assoc] using valueAt_append r' q r (pre ++ [true]) _

/-! ### the cache only ever holds values of the tree -/

/-- cache coherence: every stored entry is the value the tree defines for that node -/
def Coh (t : Tree T) (top : V × V) (ch : Cache V) : Prop :=
  ∀ kv ∈ ch.vals, valueAt o top t kv.1 [] = some kv.2

theorem coh_refines {t t' : Tree T} {top : V × V} {ch : Cache V} (h : Coh o t top ch) (hr : Refines t t') :
    Coh o t' top ch := fun kv hm => valueAt_refines o hr (h kv hm)

theorem lookup_mem {ch : Cache V} {p : Path} {v : V × V} (h : ch.lookup p = some v) : (p, v) ∈ ch.vals := by
  unfold Cache.lookup at h
  obtain ⟨kv, hf, rfl⟩ := Option.map_eq_some_iff.mp h
  have hm := List.mem_of_find?_eq_some hf
  have hk := List.find?_some hf
  have : kv.1 = p := by simpa using hk
  rw [← this]; exact hm

theorem insert_vals (ch : Cache V) (p : Path) (v : V × V) :
    ∀ kv ∈ (ch.insert p v).vals, kv = (p, v) ∨ kv ∈ ch.vals := by
  intro kv hm
  unfold Cache.insert at hm
  split at hm
  · exact Or.inr hm
  · simp only [List.mem_cons, List.mem_filter] at hm
    rcases hm with h | h
    · exact Or.inl h
    · exact Or.inr h.1
  · split at hm
    · simp only [List.mem_cons, List.mem_filter] at hm
      rcases hm with h | h
      · exact Or.inl h
      · exact Or.inr h.1
    · split at hm
      · split at hm
        · exact Or.inr hm
        · simp only [List.mem_cons, List.mem_filter] at hm
          rcases hm with h | h
          · exact Or.inl h
          · exact Or.inr h.1
      · simp only [List.mem_cons, List.mem_filter] at hm
        rcases hm with h | h
        · exact Or.inl h
        · exact Or.inr h.1

theorem coh_insert {t : Tree T} {top : V × V} {ch : Cache V} {p : Path} {v : V × V} (h : Coh o t top ch)
    (hv : valueAt o top t p [] = some v) : Coh o t top (ch.insert p v) := by
  intro kv hm
  rcases insert_vals ch p v kv hm with rfl | h'
  · exact hv
  · exact h kv h'

/-- coming back down computes the tree's values and keeps the cache coherent -/
theorem cacheDown_spec (t : Tree T) (top : V × V) : ∀ (sub : Tree T) (v : V × V) (q rest : Path) (ch : Cache V)
    {w ch'}, t.get? q = some sub → valueAt o top t q [] = some v → Coh o t top ch →
    cacheDown o sub v q rest ch = some (w, ch') →
    valueAt o top t (q ++ rest) [] = some w ∧ Coh o t top ch'
  | sub, v, q, [], ch, w, ch', _, hv, hc, h => by
      simp only [cacheDown, Option.some.injEq, Prod.mk.injEq] at h
      obtain ⟨rfl, rfl⟩ := h
      exact ⟨by simpa using hv, hc⟩
  | Tree.leaf _ _, _, _, _ :: _, _, _, _, _, _, _, h => by simp [cacheDown] at h
  | Tree.node s e m l r, v, q, b :: rest, ch, w, ch', hg, hv, hc, h => by
      simp only [cacheDown] at h
      have hval : valueAt o top t (q ++ [b]) [] =
          some (o.bridge s m e (!b) v (o.noise q false) (o.noise q true)) := by
        rw [valueAt_append, hg, hv]
        simp [valueAt]
      have hget : t.get? (q ++ [b]) = some (if b then r else l) := by
        have := get_append t q [b]
        rw [this, hg]
        cases b <;> simp [Tree.get?]
      have := cacheDown_spec t top (if b then r else l) _ (q ++ [b]) rest _ hget hval (coh_insert o hc hval) h
      simpa [List.append_assoc] using this

theorem valueAt_nil (t : Tree T) (top : V × V) (pre : Path) : valueAt o top t [] pre = some top := by
  cases t <;> rfl

theorem cacheUp_spec (ch : Cache V) : ∀ (n : Nat) (p : Path),
    ∃ r, p = cacheUp ch n p ++ r ∧ (cacheUp ch n p = [] ∨ (ch.lookup (cacheUp ch n p)).isSome = true)
  | 0, p => ⟨p, by simp [cacheUp], Or.inl rfl⟩
  | n + 1, p => by
      unfold cacheUp
      split
      · exact ⟨p, by simp, Or.inl rfl⟩
      · split
        · rename_i h; exact ⟨[], by simp, Or.inr h⟩
        · obtain ⟨r, hr, hq⟩ := cacheUp_spec ch n p.dropLast
          obtain ⟨t, ht⟩ := List.dropLast_prefix p
          exact ⟨r ++ t, by rw [← List.append_assoc, ← hr, ht], hq⟩

/-- **The cache is transparent**: what `_increment_and_space_time_levy_area` returns through the cache is the value the
tree defines for the node, and the cache stays coherent. -/
theorem cachedValue_spec {t : Tree T} {top : V × V} {ch ch' : Cache V} {p : Path} {v : V × V}
    (hc : Coh o t top ch) (h : cachedValue o t top ch p = some (v, ch')) :
    valueAt o top t p [] = some v ∧ Coh o t top ch' := by
  unfold cachedValue at h
  obtain ⟨r, hr, hq⟩ := cacheUp_spec ch (p.length + 1) p
  generalize cacheUp ch (p.length + 1) p = q at h hr hq
  simp only at h
  split at h
  · rename_i v0 sub hstart hget
    have hdrop : p.drop q.length = r := by rw [hr]; simp
    rw [hdrop] at h
    have hv0 : valueAt o top t q [] = some v0 := by
      rcases hq with rfl | hq
      · simp only [List.isEmpty_nil, if_true, Option.some.injEq] at hstart
        rw [← hstart]; exact valueAt_nil o t top []
      · by_cases hemp : q.isEmpty = true
        · have : q = [] := by simpa using hemp
          subst this
          simp only [List.isEmpty_nil, if_true, Option.some.injEq] at hstart
          rw [← hstart]; exact valueAt_nil o t top []
        · simp only [hemp, Bool.false_eq_true, if_false] at hstart
          exact hc _ (lookup_mem hstart)
    have := cacheDown_spec o t top sub v0 q r ch hget hv0 hc h
    rw [← hr] at this
    exact this
  · simp at h

/-! ### the answer is a function of the located pieces and the tree -/

/-- the aggregation `__call__` performs, with the cache taken out -/
def foldSpec (t : Tree T) (top : V × V) (ta : T) : V × V → List Path → Option (V × V)
  | acc, [] => some acc
  | acc, p :: more =>
    match valueAt o top t p [], t.get? p with
    | some v, some nd => foldSpec t top ta (o.agg ta acc nd.s nd.e v) more
    | _, _ => none

theorem foldPieces_spec {t : Tree T} {top : V × V} {ta : T} : ∀ {ps : List Path} {ch ch' : Cache V} {acc wh : V × V},
    Coh o t top ch → foldPieces o t top ta ch acc ps = some (wh, ch') →
    foldSpec o t top ta acc ps = some wh ∧ Coh o t top ch'
  | [], ch, ch', acc, wh, hc, h => by
      simp only [foldPieces, Option.some.injEq, Prod.mk.injEq] at h
      obtain ⟨rfl, rfl⟩ := h
      exact ⟨rfl, hc⟩
  | p :: more, ch, ch', acc, wh, hc, h => by
      simp only [foldPieces] at h
      split at h
      · rename_i v ch1 nd hcv hget
        obtain ⟨hv, hc1⟩ := cachedValue_spec o hc hcv
        obtain ⟨hf, hc2⟩ := foldPieces_spec hc1 h
        exact ⟨by simp only [foldSpec, hv, hget]; exact hf, hc2⟩
      · simp at h

theorem foldSpec_refines {t t' : Tree T} {top : V × V} {ta : T} (hr : Refines t t') :
    ∀ {ps : List Path} {acc wh : V × V}, foldSpec o t top ta acc ps = some wh → foldSpec o t' top ta acc ps = some wh
  | [], acc, wh, h => h
  | p :: more, acc, wh, h => by
      simp only [foldSpec] at h ⊢
      split at h
      · rename_i v nd hv hg
        obtain ⟨nd', hg', hrn⟩ := get_refines hr hg
        rw [valueAt_refines o hr hv, hg']
        simp only
        rw [hrn.bounds.1, hrn.bounds.2]
        exact foldSpec_refines hr h
      · simp at h

/-- what a non-degenerate query returns, as a function of the tree and the located pieces -/
def answerSpec (t : Tree T) (top : V × V) (ta tb : T) : List Path → Option (V × V)
  | [] => none
  | p0 :: rest =>
    match valueAt o top t p0 [] with
    | none => none
    | some v0 =>
      match foldSpec o t top ta v0 rest with
      | none => none
      | some wh => some (wh.1, o.toU wh ta tb)

theorem answerSpec_refines {t t' : Tree T} {top : V × V} {ta tb : T} (hr : Refines t t') {ps : List Path} {r : V × V}
    (h : answerSpec o t top ta tb ps = some r) : answerSpec o t' top ta tb ps = some r := by
  cases ps with
  | nil => simp [answerSpec] at h
  | cons p0 rest =>
      simp only [answerSpec] at h ⊢
      split at h
      · simp at h
      · rename_i v0 hv
        rw [valueAt_refines o hr hv]
        simp only
        split at h
        · simp at h
        · rename_i wh hf
          rw [foldSpec_refines o hr hf]
          exact h

/-! ### the object: invariants of `__call__` -/

variable (a : Arith T)

/-- the state invariant: a strictly well-formed tree and a coherent cache -/
structure Good (st : State T V) : Prop where
  wf : WF c st.tree
  coh : Coh o st.tree st.top st.cache

/-- the dependency-tree refinement only refines -/
theorem depGo_spec (hc : Sound c) (fuel : Nat) (pl : T) : ∀ (n : Nat) (t : Tree T) (stack : List Path) {t' : Tree T},
    depGo c a fuel pl n t stack = some t' → WF c t →
    Refines t t' ∧ WF c t' ∧ t'.s = t.s ∧ t'.e = t.e
  | n, t, [], t', h, hwf => by
      cases n <;> (simp only [depGo, Option.some.injEq] at h; subst h; exact ⟨Refines.refl _, hwf, rfl, rfl⟩)
  | 0, t, _ :: _, t', h, _ => by simp [depGo] at h
  | n + 1, t, p :: rest, t', h, hwf => by
      simp only [depGo] at h
      split at h
      · simp at h
      · rename_i nd hget
        obtain ⟨b1, b2, wnd⟩ := get_bounds hwf hget
        obtain ⟨rs, re, _⟩ := wf_rnd wnd
        split at h
        · split at h
          · rename_i hcond
            simp only [hc.lt, Bool.and_eq_true, decide_eq_true_eq] at hcond
            split at h
            · simp at h
            · rename_i t1 ps1 d1 hloc
              have hm : c.rnd (c.rnd (a.mid2 nd.s nd.e)) = c.rnd (a.mid2 nd.s nd.e) := hc.rnd_idem _
              obtain ⟨r1, w1, e1, e2, _⟩ := loc_spec hc hloc hwf (by rw [rs]; exact b1)
                (by rw [hm]; exact le_trans (le_of_lt hcond.2) b2) (by rw [rs, hm]; exact hcond.1)
              obtain ⟨r2, w2, e3, e4⟩ := depGo_spec hc fuel pl n t1 _ h w1
              exact ⟨r1.trans r2, w2, e3.trans e1, e4.trans e2⟩
          · exact depGo_spec hc fuel pl n t rest h hwf
        · exact depGo_spec hc fuel pl n t rest h hwf

theorem depTree_spec (hc : Sound c) {fuel : Nat} {st st' : State T V} {dt : T}
    (h : depTree c a fuel st dt = some st') (hg : Good (c := c) o st) :
    Good (c := c) o st' ∧ Refines st.tree st'.tree ∧ st'.top = st.top ∧ st'.tree.s = st.tree.s ∧
      st'.tree.e = st.tree.e ∧ st'.cache = st.cache ∧ st'.dt = st.dt := by
  unfold depTree at h
  simp only at h
  split at h
  · simp at h
  · rename_i t' hgo
    simp only [Option.some.injEq] at h
    subst h
    obtain ⟨r, w, e1, e2⟩ := depGo_spec a hc fuel _ fuel st.tree [[]] hgo hg.wf
    exact ⟨⟨w, coh_refines o hg.coh r⟩, r, rfl, e1, e2, rfl, rfl⟩

theorem statsPhase_spec (hc : Sound c) {fuel : Nat} {st st1 : State T V} {ta tb : T}
    (h : statsPhase c a fuel st ta tb = some st1) (hg : Good (c := c) o st) :
    Good (c := c) o st1 ∧ Refines st.tree st1.tree ∧ st1.top = st.top ∧ st1.tree.s = st.tree.s ∧
      st1.tree.e = st.tree.e := by
  unfold statsPhase at h
  split at h
  · simp only at h
    split at h
    · split at h
      · obtain ⟨g, r, t1, e1, e2, _, _⟩ := depTree_spec o a hc h (st := { st with numEval := _, avgDt := _ })
          ⟨hg.wf, hg.coh⟩
        exact ⟨g, r, t1, e1, e2⟩
      · simp only [Option.some.injEq] at h; subst h
        exact ⟨⟨hg.wf, hg.coh⟩, Refines.refl _, rfl, rfl, rfl⟩
    · simp only [Option.some.injEq] at h; subst h
      exact ⟨⟨hg.wf, hg.coh⟩, Refines.refl _, rfl, rfl, rfl⟩
  · simp only [Option.some.injEq] at h; subst h
    exact ⟨hg, Refines.refl _, rfl, rfl, rfl⟩

/-- what one in-range `__call__` does -/
theorem call_spec (hc : Sound c) {fuel : Nat} {st st' : State T V} {ta tb : T} {ans : Ans V}
    (hg : Good (c := c) o st) (h1 : st.tree.s ≤ ta) (h2 : ta ≤ tb) (h3 : tb ≤ st.tree.e)
    (h : call c o a fuel st ta tb = some (st', ans)) :
    Good (c := c) o st' ∧ Refines st.tree st'.tree ∧ st'.top = st.top ∧ st'.tree.s = st.tree.s ∧
      st'.tree.e = st.tree.e ∧
      ((c.rnd ta = c.rnd tb ∧ ans.W = o.zero ∧ ans.U = o.zero) ∨
       (c.rnd ta < c.rnd tb ∧ ∃ ps, find st'.tree (c.rnd ta) (c.rnd tb) = some ps ∧
          answerSpec o st'.tree st.top ta tb ps = some (ans.W, ans.U))) := by
  unfold call at h
  have c1 : c.lt ta st.tree.s = false := by rw [hc.lt]; simpa using h1
  have c2 : c.lt tb st.tree.s = false := by rw [hc.lt]; simpa using le_trans h1 h2
  have c3 : c.lt st.tree.e ta = false := by rw [hc.lt]; simpa using le_trans h2 h3
  have c4 : c.lt st.tree.e tb = false := by rw [hc.lt]; simpa using h3
  have c5 : c.lt tb ta = false := by rw [hc.lt]; simpa using h2
  simp only [c1, c2, c3, c4, c5, Bool.false_eq_true, if_false] at h
  split at h
  · rename_i hz
    simp only [hc.eq, decide_eq_true_eq] at hz
    simp only [Option.some.injEq, Prod.mk.injEq] at h
    obtain ⟨rfl, rfl⟩ := h
    exact ⟨hg, Refines.refl _, rfl, rfl, rfl, Or.inl ⟨hz, rfl, rfl⟩⟩
  · rename_i hz
    simp only [hc.eq, decide_eq_true_eq] at hz
    have hlt : c.rnd ta < c.rnd tb := lt_of_le_of_ne (hc.rnd_mono _ _ h2) hz
    split at h
    · simp at h
    · rename_i st1 hst1
      have hst1' := statsPhase_spec o a hc hst1 hg
      obtain ⟨g1, r1, t1, e1, e2⟩ := hst1'
      split at h
      · simp at h
      · rename_i tree' ps sd hloc
        have hs' : st1.tree.s ≤ c.rnd ta := by
          rw [e1, ← (wf_rnd hg.wf).1]; exact hc.rnd_mono _ _ h1
        have he' : c.rnd tb ≤ st1.tree.e := by
          rw [e2, ← (wf_rnd hg.wf).2.1]; exact hc.rnd_mono _ _ h3
        obtain ⟨r2, w2, e3, e4, f2⟩ := loc_spec hc hloc g1.wf hs' he' hlt
        split at h
        · simp at h
        · rename_i p0 prest
          split at h
          · simp at h
          · rename_i v0 ch0 hcv
            have hcoh' : Coh o tree' st1.top st1.cache := coh_refines o g1.coh r2
            obtain ⟨hv0, hc0⟩ := cachedValue_spec o hcoh' hcv
            split at h
            · simp at h
            · rename_i wh ch' hfold
              obtain ⟨hf, hc'⟩ := foldPieces_spec o hc0 hfold
              simp only [Option.some.injEq, Prod.mk.injEq] at h
              obtain ⟨rfl, rfl⟩ := h
              refine ⟨⟨w2, hc'⟩, r1.trans r2, t1, e3.trans e1, e4.trans e2, Or.inr ⟨hlt, _, f2, ?_⟩⟩
              simp only [answerSpec, ← t1, hv0, hf]

/-- any sequence of in-range queries (any number, any order, any fuel) -/
inductive Reach : State T V → State T V → Prop
  | refl (st) : Reach st st
  | step {st st' st'' : State T V} {fuel : Nat} {ta tb : T} {ans : Ans V} :
      st.tree.s ≤ ta → ta ≤ tb → tb ≤ st.tree.e → call c o a fuel st ta tb = some (st', ans) →
      Reach st' st'' → Reach st st''

theorem reach_spec (hc : Sound c) {st st' : State T V} (h : Reach (c := c) o a st st') (hg : Good (c := c) o st) :
    Good (c := c) o st' ∧ Refines st.tree st'.tree ∧ st'.top = st.top ∧ st'.tree.s = st.tree.s ∧
      st'.tree.e = st.tree.e := by
  induction h with
  | refl st => exact ⟨hg, Refines.refl _, rfl, rfl, rfl⟩
  | step h1 h2 h3 hcall _ ih =>
      obtain ⟨g1, r1, t1, e1, e2, _⟩ := call_spec o a hc hg h1 h2 h3 hcall
      obtain ⟨g2, r2, t2, e3, e4⟩ := ih g1
      exact ⟨g2, r1.trans r2, t2.trans t1, e3.trans e1, e4.trans e2⟩

/-- **C05.** Asking the same Brownian object for the same interval again returns the same `W` and `U`, no matter which
and how many other intervals were queried in between (`Reach`), whether cached values were evicted (any `cache_size`;
the cache only ever holds values of the tree), or whether the tree was refined meanwhile — by other queries or by
the dependency-tree construction firing mid-history. -/
theorem requery_identical (hc : Sound c) {fuel fuel' : Nat} {st0 st1 st2 st3 : State T V} {ta tb : T} {a1 a2 : Ans V}
    (hg : Good (c := c) o st0) (h1 : st0.tree.s ≤ ta) (h2 : ta ≤ tb) (h3 : tb ≤ st0.tree.e)
    (q1 : call c o a fuel st0 ta tb = some (st1, a1))
    (between : Reach (c := c) o a st1 st2)
    (q2 : call c o a fuel' st2 ta tb = some (st3, a2)) :
    a2.W = a1.W ∧ a2.U = a1.U := by
  obtain ⟨g1, r1, t1, e1, e2, ans1⟩ := call_spec o a hc hg h1 h2 h3 q1
  obtain ⟨g2, r2, t2, e3, e4⟩ := reach_spec o a hc between g1
  have h1' : st2.tree.s ≤ ta := by rw [e3, e1]; exact h1
  have h3' : tb ≤ st2.tree.e := by rw [e4, e2]; exact h3
  obtain ⟨_, r3, _, _, _, ans2⟩ := call_spec o a hc g2 h1' h2 h3' q2
  rcases ans1 with ⟨hz, w1, u1⟩ | ⟨hlt, ps1, f1, s1⟩
  · rcases ans2 with ⟨_, w2, u2⟩ | ⟨hlt2, _⟩
    · exact ⟨w2.trans w1.symm, u2.trans u1.symm⟩
    · exact absurd hz (ne_of_lt hlt2)
  · rcases ans2 with ⟨hz2, _⟩ | ⟨_, ps2, f2, s2⟩
    · exact absurd hz2 (ne_of_lt hlt)
    · have href : Refines st1.tree st3.tree := r2.trans r3
      have hf := find_refines f1 href
      rw [f2] at hf
      have hps : ps2 = ps1 := Option.some.inj hf
      subst hps
      have := answerSpec_refines o href s1
      rw [t2, t1] at s2
      rw [this] at s2
      have := Option.some.inj s2
      exact ⟨(congrArg Prod.fst this).symm, (congrArg Prod.snd this).symm⟩

/-- non-vacuity: a freshly constructed object (a single leaf `[t0, t1]` with rounded end points, empty cache) is `Good`. -/
example (t0 t1 : T) (h : t0 < t1) (h0 : c.rnd t0 = t0) (h1 : c.rnd t1 = t1) (top : V × V) (cap : Option Nat) :
    Good (c := c) o (State.mk (Tree.leaf t0 t1) [] ⟨cap, [], []⟩ top (-100) t0 t1 none cap : State T V) :=
  ⟨⟨h, h0, h1⟩, fun kv hm => by simp at hm⟩

end C05
