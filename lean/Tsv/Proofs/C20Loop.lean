/-
C20 — trajectory level: the fixed-step loop commutes with any projection that the step and the interpolation commute with.

`π : Y → Yr` is "take batch row i" (and `ρ` the same on the extra solver state).  If one solver step on the whole batch,
projected to row i, is the row-level step on the projected inputs (this is what `C20.*_rowwise` prove for the regenerated
steps, with the row of the Brownian motion inside `stepR`) and `linear_interp` is row-wise, then the whole `integrate`
output projected to row i is the row-level `integrate` on row i of `y0` — for every `ts`, every step size, any number of
steps.  Consequences: `row_independent` (two batched runs that agree on row i of y0 and of the Brownian motion return the
same row i, whatever the other rows contain) and `perm_equivariant`.
Law-free: `Y`, `X`, the step and the projection are arbitrary, so the statement is about bit patterns, not real numbers.
-/
import Tsv.Model.Loop

namespace C20Loop
open Model.Loop

variable {T Y X Yr Xr : Type} [LT T] [DecidableRel (fun a b : T => a < b)]
variable (plus : T → T) (tEnd : T)
variable (step : T → T → Y → X → Y × X) (interp : T → Y → T → Y → T → Y)
variable (stepR : T → T → Yr → Xr → Yr × Xr) (interpR : T → Yr → T → Yr → T → Yr)
variable (π : Y → Yr) (ρ : X → Xr)

/-- projection of a loop state -/
def projSt (s : St T Y X) : St T Yr Xr :=
  { pt := s.pt, py := π s.py, ct := s.ct, cy := π s.cy, cx := ρ s.cx }

/-- the step and the interpolation act row-wise -/
structure RowWise : Prop where
  step_y : ∀ t0 t1 y x, π (step t0 t1 y x).1 = (stepR t0 t1 (π y) (ρ x)).1
  step_x : ∀ t0 t1 y x, ρ (step t0 t1 y x).2 = (stepR t0 t1 (π y) (ρ x)).2
  interp : ∀ t0 y0 t1 y1 t, π (interp t0 y0 t1 y1 t) = interpR t0 (π y0) t1 (π y1) t

variable {step interp stepR interpR π ρ}

theorem iter_proj (h : RowWise step interp stepR interpR π ρ) (s : St T Y X) :
    projSt π ρ (iter plus tEnd step s) = iter plus tEnd stepR (projSt π ρ s) := by
  simp only [projSt, iter, h.step_y, h.step_x]

theorem advance_proj (h : RowWise step interp stepR interpR π ρ) :
    ∀ (fuel : Nat) (out : T) (s : St T Y X) (log : List (T × T)),
      advance plus tEnd stepR fuel out (projSt π ρ s) log
        = (advance plus tEnd step fuel out s log).map (fun r => (projSt π ρ r.1, r.2))
  | 0, _, _, _ => by simp [advance]
  | fuel + 1, out, s, log => by
      unfold advance
      have hct : (projSt π ρ s).ct = s.ct := rfl
      rw [hct]
      split
      · rw [← iter_proj plus tEnd h s]
        exact advance_proj h fuel out _ _
      · simp

theorem outputs_proj (h : RowWise step interp stepR interpR π ρ) (fuel : Nat) :
    ∀ (rest : List T) (s : St T Y X) (log : List (T × T)),
      outputs plus tEnd stepR interpR fuel rest (projSt π ρ s) log
        = (outputs plus tEnd step interp fuel rest s log).map (fun r => (r.1.map π, projSt π ρ r.2.1, r.2.2))
  | [], s, log => by simp [outputs]
  | out :: rest, s, log => by
      unfold outputs
      rw [advance_proj plus tEnd h fuel out s log]
      cases hadv : advance plus tEnd step fuel out s log with
      | none => simp
      | some r =>
          obtain ⟨s', log'⟩ := r
          simp only [Option.map_some]
          rw [outputs_proj h fuel rest s' log']
          cases outputs plus tEnd step interp fuel rest s' log' with
          | none => simp
          | some q =>
              obtain ⟨ys, sf, lf⟩ := q
              simp [projSt, h.interp]

/-- **Row-wise integration**: the batched `integrate`, projected to a row, is the row-level `integrate`. -/
theorem integrate_rowwise (h : RowWise step interp stepR interpR π ρ) (fuel : Nat) (y0 : Y) (t0 : T) (rest : List T)
    (x0 : X) :
    integrate plus tEnd stepR interpR fuel (π y0) t0 rest (ρ x0)
      = (integrate plus tEnd step interp fuel y0 t0 rest x0).map (fun r => (r.1.map π, projSt π ρ r.2.1, r.2.2)) := by
  unfold integrate
  have := outputs_proj plus tEnd h fuel rest { pt := t0, py := y0, ct := t0, cy := y0, cx := x0 } []
  simp only [projSt] at this
  rw [this]
  cases outputs plus tEnd step interp fuel rest { pt := t0, py := y0, ct := t0, cy := y0, cx := x0 } [] with
  | none => simp
  | some q => obtain ⟨ys, sf, lf⟩ := q; simp [projSt]

/-- **No cross-talk**: two batched runs (different batches, different Brownian motions — hence different `step`s) whose row
`i` data agree (`π y0 = π' y0'`, `ρ x0 = ρ' x0'`, and both steps project to the SAME row-level step) return the same row `i`
at every output time. -/
theorem row_independent {Y' X' : Type} {step' : T → T → Y' → X' → Y' × X'} {interp' : T → Y' → T → Y' → T → Y'}
    {π' : Y' → Yr} {ρ' : X' → Xr}
    (h : RowWise step interp stepR interpR π ρ) (h' : RowWise step' interp' stepR interpR π' ρ')
    (fuel : Nat) (y0 : Y) (y0' : Y') (t0 : T) (rest : List T) (x0 : X) (x0' : X')
    (hy : π y0 = π' y0') (hx : ρ x0 = ρ' x0') {ys sf lf ys' sf' lf'}
    (r : integrate plus tEnd step interp fuel y0 t0 rest x0 = some (ys, sf, lf))
    (r' : integrate plus tEnd step' interp' fuel y0' t0 rest x0' = some (ys', sf', lf')) :
    ys.map π = ys'.map π' := by
  have a := integrate_rowwise plus tEnd h fuel y0 t0 rest x0
  have b := integrate_rowwise plus tEnd h' fuel y0' t0 rest x0'
  rw [r] at a
  rw [r', ← hy, ← hx, a] at b
  simp only [Option.map_some, Option.some.injEq, Prod.mk.injEq] at b
  exact b.1

/-- **Permutation equivariance**: if `σ` re-indexes the rows (`π i ∘ perm = π (σ i)`), running on the permuted batch gives
the permuted outputs.  Stated for one row `i` and its image; it is `row_independent` with `π' = π (σ i)`. -/
theorem perm_equivariant {step' : T → T → Y → X → Y × X} {πj : Y → Yr} {ρj : X → Xr}
    (h : RowWise step interp stepR interpR π ρ) (h' : RowWise step' interp stepR interpR πj ρj)
    (fuel : Nat) (y0 yp : Y) (t0 : T) (rest : List T) (x0 xp : X)
    (hy : π y0 = πj yp) (hx : ρ x0 = ρj xp) {ys sf lf ys' sf' lf'}
    (r : integrate plus tEnd step interp fuel y0 t0 rest x0 = some (ys, sf, lf))
    (r' : integrate plus tEnd step' interp fuel yp t0 rest xp = some (ys', sf', lf')) :
    ys.map π = ys'.map πj :=
  row_independent plus tEnd h h' fuel y0 yp t0 rest x0 xp hy hx r r'

/-- non-vacuity: a two-row Euler-like step on pairs of naturals is row-wise for the first projection -/
example : RowWise (T := Nat) (fun _ t1 (y : Nat × Nat) (_ : Unit) => ((y.1 + t1, y.2 + 2 * t1), ()))
    (fun _ y0 _ _ _ => y0) (fun _ t1 (y : Nat) (_ : Unit) => (y + t1, ())) (fun _ y0 _ _ _ => y0) Prod.fst id :=
  ⟨fun _ _ _ _ => rfl, fun _ _ _ _ => rfl, fun _ _ _ _ _ => rfl⟩

end C20Loop
