/-
C18 (exact case): when `f − h = g c` for a constant `c` and `|g| > 1e-7` (so that `stable_division` divides by `g`
itself), the log-ratio increment over a step is exactly `½ c² · dt` — for Euler, Heun (two stages, weights ½ + ½) and
SRK/SRID2 (weights 1/6 + 1/6 + 2/3 + 0): the integrand is the constant `½ c²` at every stage and the weights sum to one.
-/
import Tsv.Gen.Logqp
import Mathlib.Tactic.Ring
import Mathlib.Tactic.FieldSimp
import Mathlib.Tactic.Positivity
import Mathlib.Tactic.Linarith
import Mathlib.Algebra.Order.Field.Basic

namespace C18
set_option linter.unusedSectionVars false
variable {K : Type} [Field K] [LinearOrder K] [IsStrictOrderedRing K]

/-- `½ ((f − (f − g c)) / g)² = ½ c²` when `g ≠ 0` -/
theorem integrand_const (F G c : K) (hG : G ≠ 0) : (1 / 2 : K) * ((F - (F - G * c)) / G) ^ 2 = (1 / 2) * c ^ 2 := by
  field_simp; ring

variable (sgn : K → K) (f g : K → K → K) (c : K) (hg : ∀ t y, (1 : K) / 10000000 < |g t y|)
include hg

theorem g_ne (t y : K) : g t y ≠ 0 := by
  intro h0; have := hg t y; rw [h0, abs_zero] at this; norm_num at this

theorem euler_const_exact (t0 dt y0 l0 w0 w1 : K) :
    Gen.logqp_euler_i_diagonal_11_y1_0_1 sgn f g (fun t y => f t y - g t y * c) t0 (t0 + dt) y0 l0 w0 w1 - l0
      = (1 / 2) * c ^ 2 * dt := by
  simp only [Gen.logqp_euler_i_diagonal_11_y1_0_1, Gen.logqp_euler_i_diagonal_11_flq, gt_iff_lt, hg, if_true,
    integrand_const _ _ c (g_ne g hg _ _)]
  ring

theorem heun_const_exact (t0 dt y0 l0 w0 w1 : K) :
    Gen.logqp_heun_s_diagonal_11_y1_0_1 sgn f g (fun t y => f t y - g t y * c) t0 (t0 + dt) y0 l0 w0 w1 - l0
      = (1 / 2) * c ^ 2 * dt := by
  simp only [Gen.logqp_heun_s_diagonal_11_y1_0_1, Gen.logqp_heun_s_diagonal_11_flq,
    Gen.logqp_heun_s_diagonal_11_flq_1, gt_iff_lt, hg, if_true, integrand_const _ _ c (g_ne g hg _ _)]
  ring

theorem srk_const_exact (sqrt : K → K) (t0 dt y0 l0 w0 w1 u0 u1 : K) :
    Gen.logqp_srk_i_diagonal_11_y1_0_1 sqrt sgn f g (fun t y => f t y - g t y * c) t0 (t0 + dt) y0 l0 w0 w1 u0 u1 - l0
      = (1 / 2) * c ^ 2 * dt := by
  simp only [Gen.logqp_srk_i_diagonal_11_y1_0_1, Gen.logqp_srk_i_diagonal_11_flq,
    Gen.logqp_srk_i_diagonal_11_flq_1, Gen.logqp_srk_i_diagonal_11_flq_2, Gen.logqp_srk_i_diagonal_11_flq_3,
    gt_iff_lt, hg, if_true, integrand_const _ _ c (g_ne g hg _ _)]
  ring

end C18
