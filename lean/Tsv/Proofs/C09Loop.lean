/-
C09 / C10 — the real `_SdeintAdjointMethod` (torchsde/_core/adjoint.py), traced end to end.

WRITTEN BY vlib/author_c09.py; COMMITTED; re-checked against lean/Tsv/Gen/AdjLoop.lean, regenerated on every run by running the REAL
`_SdeintAdjointMethod.forward` and `.backward` on symbolic tensors (stub `ctx`; `apply` := `forward` under `no_grad`, which is what
`torch.autograd.Function` does; `ReverseBrownian` := the forward increments in reverse order) for method = reversible_heun,
adjoint_method = adjoint_reversible_heun, two output times `t0, t0+dt` (one backward segment; with more segments the later ones start
from RECONSTRUCTED extra states, whose equality with the forward ones is C15 and is not re-derived inside function arguments here —
the composition over segments is `C10Loop.adjoint_eq_backprop`), arbitrary loss weights `w0, w1` on the two outputs, uninterpreted drift / diffusion `f(t, y, θ)`, `g(t, y, θ)`:

  `fw_k = pl_k`        the values `sdeint_adjoint` returns are those `sdeint` returns (same `integrate` on the detached `y0`);
  `ad_y = bp_y`, `ad_th = bp_th`
                       the gradients `.backward` returns for `y0` and the parameter equal backprop through `sdeint` — for ANY weights, so
                       for losses on any subset of the output times: the loop `aug_state[0] = ys[i-1]; aug_state[1] += grad_ys[i-1]`, the
                       hand-over of the extra solver state between segments, the shapes/flattening and the sign conventions are
                       all exercised symbolically.
-/
import Tsv.Gen.AdjLoop
import Mathlib.Tactic.Ring
import Mathlib.Tactic.FieldSimp
import Mathlib.Algebra.CharZero.Defs

namespace C09Loop
set_option linter.unusedSectionVars false
set_option linter.unusedVariables false
set_option linter.unusedTactic false
set_option linter.unreachableTactic false
set_option linter.unusedSimpArgs false
set_option maxRecDepth 8000
variable {K : Type} [Field K] [LinearOrder K] [CharZero K]


set_option maxHeartbeats 4000000 in
/-- `adjloop_diagonal_11`: `fw_0_0_0` = `pl_0_0_0` -/
theorem adjloop_diagonal_11_fw_0_0_0 (f : K → K → K → K) (f_d1 : K → K → K → K) (f_d2 : K → K → K → K) (g : K → K → K → K) (g_d1 : K → K → K → K) (g_d2 : K → K → K → K) (t0 dt theta y0_0_0 w0_0_0 w1_0_0 dW0_0_0 : K) (hdt : dt ≠ 0) :
    Gen.adjloop_diagonal_11_fw_0_0_0 f f_d1 f_d2 g g_d1 g_d2 t0 dt theta y0_0_0 w0_0_0 w1_0_0 dW0_0_0 = Gen.adjloop_diagonal_11_pl_0_0_0 f f_d1 f_d2 g g_d1 g_d2 t0 dt theta y0_0_0 w0_0_0 w1_0_0 dW0_0_0 := by
  have e1 : t0 + 0 * dt + dt = t0 + 1 * dt := by ring
  have e2 : -(t0 + 1 * dt) + dt = -(t0 + 0 * dt) := by ring
  have e3 : -(t0 + 0 * dt) - -(t0 + 1 * dt) = dt := by ring
  have e4 : t0 + 1 * dt - (t0 + 0 * dt) = dt := by ring
  simp only [Gen.adjloop_diagonal_11_fw_0_0_0, Gen.adjloop_diagonal_11_pl_0_0_0, neg_neg, e1, e2, min_self, e3, e4]
  try (first | ring | (field_simp; ring))

set_option maxHeartbeats 4000000 in
/-- `adjloop_diagonal_11`: `fw_1_0_0` = `pl_1_0_0` -/
theorem adjloop_diagonal_11_fw_1_0_0 (f : K → K → K → K) (f_d1 : K → K → K → K) (f_d2 : K → K → K → K) (g : K → K → K → K) (g_d1 : K → K → K → K) (g_d2 : K → K → K → K) (t0 dt theta y0_0_0 w0_0_0 w1_0_0 dW0_0_0 : K) (hdt : dt ≠ 0) :
    Gen.adjloop_diagonal_11_fw_1_0_0 f f_d1 f_d2 g g_d1 g_d2 t0 dt theta y0_0_0 w0_0_0 w1_0_0 dW0_0_0 = Gen.adjloop_diagonal_11_pl_1_0_0 f f_d1 f_d2 g g_d1 g_d2 t0 dt theta y0_0_0 w0_0_0 w1_0_0 dW0_0_0 := by
  have e1 : t0 + 0 * dt + dt = t0 + 1 * dt := by ring
  have e2 : -(t0 + 1 * dt) + dt = -(t0 + 0 * dt) := by ring
  have e3 : -(t0 + 0 * dt) - -(t0 + 1 * dt) = dt := by ring
  have e4 : t0 + 1 * dt - (t0 + 0 * dt) = dt := by ring
  simp only [Gen.adjloop_diagonal_11_fw_1_0_0, Gen.adjloop_diagonal_11_pl_1_0_0, neg_neg, e1, e2, min_self, e3, e4]
  try (first | ring | (field_simp; ring))

set_option maxHeartbeats 4000000 in
/-- `adjloop_diagonal_11`: `ad_y_0_0` = `bp_y_0_0` -/
theorem adjloop_diagonal_11_ad_y_0_0 (f : K → K → K → K) (f_d1 : K → K → K → K) (f_d2 : K → K → K → K) (g : K → K → K → K) (g_d1 : K → K → K → K) (g_d2 : K → K → K → K) (t0 dt theta y0_0_0 w0_0_0 w1_0_0 dW0_0_0 : K) (hdt : dt ≠ 0) :
    Gen.adjloop_diagonal_11_ad_y_0_0 f f_d1 f_d2 g g_d1 g_d2 t0 dt theta y0_0_0 w0_0_0 w1_0_0 dW0_0_0 = Gen.adjloop_diagonal_11_bp_y_0_0 f f_d1 f_d2 g g_d1 g_d2 t0 dt theta y0_0_0 w0_0_0 w1_0_0 dW0_0_0 := by
  have e1 : t0 + 0 * dt + dt = t0 + 1 * dt := by ring
  have e2 : -(t0 + 1 * dt) + dt = -(t0 + 0 * dt) := by ring
  have e3 : -(t0 + 0 * dt) - -(t0 + 1 * dt) = dt := by ring
  have e4 : t0 + 1 * dt - (t0 + 0 * dt) = dt := by ring
  simp only [Gen.adjloop_diagonal_11_ad_y_0_0, Gen.adjloop_diagonal_11_bp_y_0_0, neg_neg, e1, e2, min_self, e3, e4]
  rw [show Gen.adjloop_diagonal_11_f_d1_ba36ce1aa217 f f_d1 f_d2 g g_d1 g_d2 t0 dt theta y0_0_0 w0_0_0 w1_0_0 dW0_0_0 = Gen.adjloop_diagonal_11_f_d1_63026597406b f f_d1 f_d2 g g_d1 g_d2 t0 dt theta y0_0_0 w0_0_0 w1_0_0 dW0_0_0 from by simp only [Gen.adjloop_diagonal_11_f_d1_ba36ce1aa217, Gen.adjloop_diagonal_11_f_d1_63026597406b, e1, e2, min_self]]
  rw [show Gen.adjloop_diagonal_11_g_d1_72076cb18aa5 f f_d1 f_d2 g g_d1 g_d2 t0 dt theta y0_0_0 w0_0_0 w1_0_0 dW0_0_0 = Gen.adjloop_diagonal_11_g_d1_706495d03ff0 f f_d1 f_d2 g g_d1 g_d2 t0 dt theta y0_0_0 w0_0_0 w1_0_0 dW0_0_0 from by simp only [Gen.adjloop_diagonal_11_g_d1_72076cb18aa5, Gen.adjloop_diagonal_11_g_d1_706495d03ff0, e1, e2, min_self]]
  try generalize Gen.adjloop_diagonal_11_f_4460654369b4 f f_d1 f_d2 g g_d1 g_d2 t0 dt theta y0_0_0 w0_0_0 w1_0_0 dW0_0_0 = a0
  try generalize Gen.adjloop_diagonal_11_f_b9b7574b1b5e f f_d1 f_d2 g g_d1 g_d2 t0 dt theta y0_0_0 w0_0_0 w1_0_0 dW0_0_0 = a1
  try generalize Gen.adjloop_diagonal_11_f_d1_21b622e4cb05 f f_d1 f_d2 g g_d1 g_d2 t0 dt theta y0_0_0 w0_0_0 w1_0_0 dW0_0_0 = a2
  try generalize Gen.adjloop_diagonal_11_f_d1_63026597406b f f_d1 f_d2 g g_d1 g_d2 t0 dt theta y0_0_0 w0_0_0 w1_0_0 dW0_0_0 = a3
  try generalize Gen.adjloop_diagonal_11_f_d1_ba36ce1aa217 f f_d1 f_d2 g g_d1 g_d2 t0 dt theta y0_0_0 w0_0_0 w1_0_0 dW0_0_0 = a4
  try generalize Gen.adjloop_diagonal_11_g_32efc6e6b11b f f_d1 f_d2 g g_d1 g_d2 t0 dt theta y0_0_0 w0_0_0 w1_0_0 dW0_0_0 = a5
  try generalize Gen.adjloop_diagonal_11_g_7f3fa59e2935 f f_d1 f_d2 g g_d1 g_d2 t0 dt theta y0_0_0 w0_0_0 w1_0_0 dW0_0_0 = a6
  try generalize Gen.adjloop_diagonal_11_g_d1_706495d03ff0 f f_d1 f_d2 g g_d1 g_d2 t0 dt theta y0_0_0 w0_0_0 w1_0_0 dW0_0_0 = a7
  try generalize Gen.adjloop_diagonal_11_g_d1_72076cb18aa5 f f_d1 f_d2 g g_d1 g_d2 t0 dt theta y0_0_0 w0_0_0 w1_0_0 dW0_0_0 = a8
  try generalize Gen.adjloop_diagonal_11_g_d1_a9716afbb519 f f_d1 f_d2 g g_d1 g_d2 t0 dt theta y0_0_0 w0_0_0 w1_0_0 dW0_0_0 = a9
  try (first | ring | (field_simp; ring))

set_option maxHeartbeats 4000000 in
/-- `adjloop_diagonal_11`: `ad_th` = `bp_th` -/
theorem adjloop_diagonal_11_ad_th (f : K → K → K → K) (f_d1 : K → K → K → K) (f_d2 : K → K → K → K) (g : K → K → K → K) (g_d1 : K → K → K → K) (g_d2 : K → K → K → K) (t0 dt theta y0_0_0 w0_0_0 w1_0_0 dW0_0_0 : K) (hdt : dt ≠ 0) :
    Gen.adjloop_diagonal_11_ad_th f f_d1 f_d2 g g_d1 g_d2 t0 dt theta y0_0_0 w0_0_0 w1_0_0 dW0_0_0 = Gen.adjloop_diagonal_11_bp_th f f_d1 f_d2 g g_d1 g_d2 t0 dt theta y0_0_0 w0_0_0 w1_0_0 dW0_0_0 := by
  have e1 : t0 + 0 * dt + dt = t0 + 1 * dt := by ring
  have e2 : -(t0 + 1 * dt) + dt = -(t0 + 0 * dt) := by ring
  have e3 : -(t0 + 0 * dt) - -(t0 + 1 * dt) = dt := by ring
  have e4 : t0 + 1 * dt - (t0 + 0 * dt) = dt := by ring
  simp only [Gen.adjloop_diagonal_11_ad_th, Gen.adjloop_diagonal_11_bp_th, neg_neg, e1, e2, min_self, e3, e4]
  rw [show Gen.adjloop_diagonal_11_f_d1_ba36ce1aa217 f f_d1 f_d2 g g_d1 g_d2 t0 dt theta y0_0_0 w0_0_0 w1_0_0 dW0_0_0 = Gen.adjloop_diagonal_11_f_d1_63026597406b f f_d1 f_d2 g g_d1 g_d2 t0 dt theta y0_0_0 w0_0_0 w1_0_0 dW0_0_0 from by simp only [Gen.adjloop_diagonal_11_f_d1_ba36ce1aa217, Gen.adjloop_diagonal_11_f_d1_63026597406b, e1, e2, min_self]]
  rw [show Gen.adjloop_diagonal_11_f_d2_68a32c836609 f f_d1 f_d2 g g_d1 g_d2 t0 dt theta y0_0_0 w0_0_0 w1_0_0 dW0_0_0 = Gen.adjloop_diagonal_11_f_d2_2c059cfea197 f f_d1 f_d2 g g_d1 g_d2 t0 dt theta y0_0_0 w0_0_0 w1_0_0 dW0_0_0 from by simp only [Gen.adjloop_diagonal_11_f_d2_68a32c836609, Gen.adjloop_diagonal_11_f_d2_2c059cfea197, e1, e2, min_self]]
  rw [show Gen.adjloop_diagonal_11_g_d1_72076cb18aa5 f f_d1 f_d2 g g_d1 g_d2 t0 dt theta y0_0_0 w0_0_0 w1_0_0 dW0_0_0 = Gen.adjloop_diagonal_11_g_d1_706495d03ff0 f f_d1 f_d2 g g_d1 g_d2 t0 dt theta y0_0_0 w0_0_0 w1_0_0 dW0_0_0 from by simp only [Gen.adjloop_diagonal_11_g_d1_72076cb18aa5, Gen.adjloop_diagonal_11_g_d1_706495d03ff0, e1, e2, min_self]]
  rw [show Gen.adjloop_diagonal_11_g_d2_c69034bf7027 f f_d1 f_d2 g g_d1 g_d2 t0 dt theta y0_0_0 w0_0_0 w1_0_0 dW0_0_0 = Gen.adjloop_diagonal_11_g_d2_4a27075d754d f f_d1 f_d2 g g_d1 g_d2 t0 dt theta y0_0_0 w0_0_0 w1_0_0 dW0_0_0 from by simp only [Gen.adjloop_diagonal_11_g_d2_c69034bf7027, Gen.adjloop_diagonal_11_g_d2_4a27075d754d, e1, e2, min_self]]
  try generalize Gen.adjloop_diagonal_11_f_4460654369b4 f f_d1 f_d2 g g_d1 g_d2 t0 dt theta y0_0_0 w0_0_0 w1_0_0 dW0_0_0 = a0
  try generalize Gen.adjloop_diagonal_11_f_b9b7574b1b5e f f_d1 f_d2 g g_d1 g_d2 t0 dt theta y0_0_0 w0_0_0 w1_0_0 dW0_0_0 = a1
  try generalize Gen.adjloop_diagonal_11_f_d1_63026597406b f f_d1 f_d2 g g_d1 g_d2 t0 dt theta y0_0_0 w0_0_0 w1_0_0 dW0_0_0 = a2
  try generalize Gen.adjloop_diagonal_11_f_d1_ba36ce1aa217 f f_d1 f_d2 g g_d1 g_d2 t0 dt theta y0_0_0 w0_0_0 w1_0_0 dW0_0_0 = a3
  try generalize Gen.adjloop_diagonal_11_f_d2_2c059cfea197 f f_d1 f_d2 g g_d1 g_d2 t0 dt theta y0_0_0 w0_0_0 w1_0_0 dW0_0_0 = a4
  try generalize Gen.adjloop_diagonal_11_f_d2_3e3107e3480f f f_d1 f_d2 g g_d1 g_d2 t0 dt theta y0_0_0 w0_0_0 w1_0_0 dW0_0_0 = a5
  try generalize Gen.adjloop_diagonal_11_f_d2_68a32c836609 f f_d1 f_d2 g g_d1 g_d2 t0 dt theta y0_0_0 w0_0_0 w1_0_0 dW0_0_0 = a6
  try generalize Gen.adjloop_diagonal_11_g_32efc6e6b11b f f_d1 f_d2 g g_d1 g_d2 t0 dt theta y0_0_0 w0_0_0 w1_0_0 dW0_0_0 = a7
  try generalize Gen.adjloop_diagonal_11_g_7f3fa59e2935 f f_d1 f_d2 g g_d1 g_d2 t0 dt theta y0_0_0 w0_0_0 w1_0_0 dW0_0_0 = a8
  try generalize Gen.adjloop_diagonal_11_g_d1_706495d03ff0 f f_d1 f_d2 g g_d1 g_d2 t0 dt theta y0_0_0 w0_0_0 w1_0_0 dW0_0_0 = a9
  try generalize Gen.adjloop_diagonal_11_g_d1_72076cb18aa5 f f_d1 f_d2 g g_d1 g_d2 t0 dt theta y0_0_0 w0_0_0 w1_0_0 dW0_0_0 = a10
  try generalize Gen.adjloop_diagonal_11_g_d2_4a27075d754d f f_d1 f_d2 g g_d1 g_d2 t0 dt theta y0_0_0 w0_0_0 w1_0_0 dW0_0_0 = a11
  try generalize Gen.adjloop_diagonal_11_g_d2_c69034bf7027 f f_d1 f_d2 g g_d1 g_d2 t0 dt theta y0_0_0 w0_0_0 w1_0_0 dW0_0_0 = a12
  try generalize Gen.adjloop_diagonal_11_g_d2_ddcc3b2c1fd3 f f_d1 f_d2 g g_d1 g_d2 t0 dt theta y0_0_0 w0_0_0 w1_0_0 dW0_0_0 = a13
  try (first | ring | (field_simp; ring))

set_option maxHeartbeats 4000000 in
/-- `adjloop_general_11`: `fw_0_0_0` = `pl_0_0_0` -/
theorem adjloop_general_11_fw_0_0_0 (f : K → K → K → K) (f_d1 : K → K → K → K) (f_d2 : K → K → K → K) (g : K → K → K → K) (g_d1 : K → K → K → K) (g_d2 : K → K → K → K) (t0 dt theta y0_0_0 w0_0_0 w1_0_0 dW0_0_0 : K) (hdt : dt ≠ 0) :
    Gen.adjloop_general_11_fw_0_0_0 f f_d1 f_d2 g g_d1 g_d2 t0 dt theta y0_0_0 w0_0_0 w1_0_0 dW0_0_0 = Gen.adjloop_general_11_pl_0_0_0 f f_d1 f_d2 g g_d1 g_d2 t0 dt theta y0_0_0 w0_0_0 w1_0_0 dW0_0_0 := by
  have e1 : t0 + 0 * dt + dt = t0 + 1 * dt := by ring
  have e2 : -(t0 + 1 * dt) + dt = -(t0 + 0 * dt) := by ring
  have e3 : -(t0 + 0 * dt) - -(t0 + 1 * dt) = dt := by ring
  have e4 : t0 + 1 * dt - (t0 + 0 * dt) = dt := by ring
  simp only [Gen.adjloop_general_11_fw_0_0_0, Gen.adjloop_general_11_pl_0_0_0, neg_neg, e1, e2, min_self, e3, e4]
  try (first | ring | (field_simp; ring))

set_option maxHeartbeats 4000000 in
/-- `adjloop_general_11`: `fw_1_0_0` = `pl_1_0_0` -/
theorem adjloop_general_11_fw_1_0_0 (f : K → K → K → K) (f_d1 : K → K → K → K) (f_d2 : K → K → K → K) (g : K → K → K → K) (g_d1 : K → K → K → K) (g_d2 : K → K → K → K) (t0 dt theta y0_0_0 w0_0_0 w1_0_0 dW0_0_0 : K) (hdt : dt ≠ 0) :
    Gen.adjloop_general_11_fw_1_0_0 f f_d1 f_d2 g g_d1 g_d2 t0 dt theta y0_0_0 w0_0_0 w1_0_0 dW0_0_0 = Gen.adjloop_general_11_pl_1_0_0 f f_d1 f_d2 g g_d1 g_d2 t0 dt theta y0_0_0 w0_0_0 w1_0_0 dW0_0_0 := by
  have e1 : t0 + 0 * dt + dt = t0 + 1 * dt := by ring
  have e2 : -(t0 + 1 * dt) + dt = -(t0 + 0 * dt) := by ring
  have e3 : -(t0 + 0 * dt) - -(t0 + 1 * dt) = dt := by ring
  have e4 : t0 + 1 * dt - (t0 + 0 * dt) = dt := by ring
  simp only [Gen.adjloop_general_11_fw_1_0_0, Gen.adjloop_general_11_pl_1_0_0, neg_neg, e1, e2, min_self, e3, e4]
  try (first | ring | (field_simp; ring))

set_option maxHeartbeats 4000000 in
/-- `adjloop_general_11`: `ad_y_0_0` = `bp_y_0_0` -/
theorem adjloop_general_11_ad_y_0_0 (f : K → K → K → K) (f_d1 : K → K → K → K) (f_d2 : K → K → K → K) (g : K → K → K → K) (g_d1 : K → K → K → K) (g_d2 : K → K → K → K) (t0 dt theta y0_0_0 w0_0_0 w1_0_0 dW0_0_0 : K) (hdt : dt ≠ 0) :
    Gen.adjloop_general_11_ad_y_0_0 f f_d1 f_d2 g g_d1 g_d2 t0 dt theta y0_0_0 w0_0_0 w1_0_0 dW0_0_0 = Gen.adjloop_general_11_bp_y_0_0 f f_d1 f_d2 g g_d1 g_d2 t0 dt theta y0_0_0 w0_0_0 w1_0_0 dW0_0_0 := by
  have e1 : t0 + 0 * dt + dt = t0 + 1 * dt := by ring
  have e2 : -(t0 + 1 * dt) + dt = -(t0 + 0 * dt) := by ring
  have e3 : -(t0 + 0 * dt) - -(t0 + 1 * dt) = dt := by ring
  have e4 : t0 + 1 * dt - (t0 + 0 * dt) = dt := by ring
  simp only [Gen.adjloop_general_11_ad_y_0_0, Gen.adjloop_general_11_bp_y_0_0, neg_neg, e1, e2, min_self, e3, e4]
  rw [show Gen.adjloop_general_11_f_d1_ba36ce1aa217 f f_d1 f_d2 g g_d1 g_d2 t0 dt theta y0_0_0 w0_0_0 w1_0_0 dW0_0_0 = Gen.adjloop_general_11_f_d1_63026597406b f f_d1 f_d2 g g_d1 g_d2 t0 dt theta y0_0_0 w0_0_0 w1_0_0 dW0_0_0 from by simp only [Gen.adjloop_general_11_f_d1_ba36ce1aa217, Gen.adjloop_general_11_f_d1_63026597406b, e1, e2, min_self]]
  rw [show Gen.adjloop_general_11_g_d1_72076cb18aa5 f f_d1 f_d2 g g_d1 g_d2 t0 dt theta y0_0_0 w0_0_0 w1_0_0 dW0_0_0 = Gen.adjloop_general_11_g_d1_706495d03ff0 f f_d1 f_d2 g g_d1 g_d2 t0 dt theta y0_0_0 w0_0_0 w1_0_0 dW0_0_0 from by simp only [Gen.adjloop_general_11_g_d1_72076cb18aa5, Gen.adjloop_general_11_g_d1_706495d03ff0, e1, e2, min_self]]
  try generalize Gen.adjloop_general_11_f_4460654369b4 f f_d1 f_d2 g g_d1 g_d2 t0 dt theta y0_0_0 w0_0_0 w1_0_0 dW0_0_0 = a0
  try generalize Gen.adjloop_general_11_f_b9b7574b1b5e f f_d1 f_d2 g g_d1 g_d2 t0 dt theta y0_0_0 w0_0_0 w1_0_0 dW0_0_0 = a1
  try generalize Gen.adjloop_general_11_f_d1_21b622e4cb05 f f_d1 f_d2 g g_d1 g_d2 t0 dt theta y0_0_0 w0_0_0 w1_0_0 dW0_0_0 = a2
  try generalize Gen.adjloop_general_11_f_d1_63026597406b f f_d1 f_d2 g g_d1 g_d2 t0 dt theta y0_0_0 w0_0_0 w1_0_0 dW0_0_0 = a3
  try generalize Gen.adjloop_general_11_f_d1_ba36ce1aa217 f f_d1 f_d2 g g_d1 g_d2 t0 dt theta y0_0_0 w0_0_0 w1_0_0 dW0_0_0 = a4
  try generalize Gen.adjloop_general_11_g_32efc6e6b11b f f_d1 f_d2 g g_d1 g_d2 t0 dt theta y0_0_0 w0_0_0 w1_0_0 dW0_0_0 = a5
  try generalize Gen.adjloop_general_11_g_7f3fa59e2935 f f_d1 f_d2 g g_d1 g_d2 t0 dt theta y0_0_0 w0_0_0 w1_0_0 dW0_0_0 = a6
  try generalize Gen.adjloop_general_11_g_d1_706495d03ff0 f f_d1 f_d2 g g_d1 g_d2 t0 dt theta y0_0_0 w0_0_0 w1_0_0 dW0_0_0 = a7
  try generalize Gen.adjloop_general_11_g_d1_72076cb18aa5 f f_d1 f_d2 g g_d1 g_d2 t0 dt theta y0_0_0 w0_0_0 w1_0_0 dW0_0_0 = a8
  try generalize Gen.adjloop_general_11_g_d1_a9716afbb519 f f_d1 f_d2 g g_d1 g_d2 t0 dt theta y0_0_0 w0_0_0 w1_0_0 dW0_0_0 = a9
  try (first | ring | (field_simp; ring))

set_option maxHeartbeats 4000000 in
/-- `adjloop_general_11`: `ad_th` = `bp_th` -/
theorem adjloop_general_11_ad_th (f : K → K → K → K) (f_d1 : K → K → K → K) (f_d2 : K → K → K → K) (g : K → K → K → K) (g_d1 : K → K → K → K) (g_d2 : K → K → K → K) (t0 dt theta y0_0_0 w0_0_0 w1_0_0 dW0_0_0 : K) (hdt : dt ≠ 0) :
    Gen.adjloop_general_11_ad_th f f_d1 f_d2 g g_d1 g_d2 t0 dt theta y0_0_0 w0_0_0 w1_0_0 dW0_0_0 = Gen.adjloop_general_11_bp_th f f_d1 f_d2 g g_d1 g_d2 t0 dt theta y0_0_0 w0_0_0 w1_0_0 dW0_0_0 := by
  have e1 : t0 + 0 * dt + dt = t0 + 1 * dt := by ring
  have e2 : -(t0 + 1 * dt) + dt = -(t0 + 0 * dt) := by ring
  have e3 : -(t0 + 0 * dt) - -(t0 + 1 * dt) = dt := by ring
  have e4 : t0 + 1 * dt - (t0 + 0 * dt) = dt := by ring
  simp only [Gen.adjloop_general_11_ad_th, Gen.adjloop_general_11_bp_th, neg_neg, e1, e2, min_self, e3, e4]
  rw [show Gen.adjloop_general_11_f_d1_ba36ce1aa217 f f_d1 f_d2 g g_d1 g_d2 t0 dt theta y0_0_0 w0_0_0 w1_0_0 dW0_0_0 = Gen.adjloop_general_11_f_d1_63026597406b f f_d1 f_d2 g g_d1 g_d2 t0 dt theta y0_0_0 w0_0_0 w1_0_0 dW0_0_0 from by simp only [Gen.adjloop_general_11_f_d1_ba36ce1aa217, Gen.adjloop_general_11_f_d1_63026597406b, e1, e2, min_self]]
  rw [show Gen.adjloop_general_11_f_d2_68a32c836609 f f_d1 f_d2 g g_d1 g_d2 t0 dt theta y0_0_0 w0_0_0 w1_0_0 dW0_0_0 = Gen.adjloop_general_11_f_d2_2c059cfea197 f f_d1 f_d2 g g_d1 g_d2 t0 dt theta y0_0_0 w0_0_0 w1_0_0 dW0_0_0 from by simp only [Gen.adjloop_general_11_f_d2_68a32c836609, Gen.adjloop_general_11_f_d2_2c059cfea197, e1, e2, min_self]]
  rw [show Gen.adjloop_general_11_g_d1_72076cb18aa5 f f_d1 f_d2 g g_d1 g_d2 t0 dt theta y0_0_0 w0_0_0 w1_0_0 dW0_0_0 = Gen.adjloop_general_11_g_d1_706495d03ff0 f f_d1 f_d2 g g_d1 g_d2 t0 dt theta y0_0_0 w0_0_0 w1_0_0 dW0_0_0 from by simp only [Gen.adjloop_general_11_g_d1_72076cb18aa5, Gen.adjloop_general_11_g_d1_706495d03ff0, e1, e2, min_self]]
  rw [show Gen.adjloop_general_11_g_d2_c69034bf7027 f f_d1 f_d2 g g_d1 g_d2 t0 dt theta y0_0_0 w0_0_0 w1_0_0 dW0_0_0 = Gen.adjloop_general_11_g_d2_4a27075d754d f f_d1 f_d2 g g_d1 g_d2 t0 dt theta y0_0_0 w0_0_0 w1_0_0 dW0_0_0 from by simp only [Gen.adjloop_general_11_g_d2_c69034bf7027, Gen.adjloop_general_11_g_d2_4a27075d754d, e1, e2, min_self]]
  try generalize Gen.adjloop_general_11_f_4460654369b4 f f_d1 f_d2 g g_d1 g_d2 t0 dt theta y0_0_0 w0_0_0 w1_0_0 dW0_0_0 = a0
  try generalize Gen.adjloop_general_11_f_b9b7574b1b5e f f_d1 f_d2 g g_d1 g_d2 t0 dt theta y0_0_0 w0_0_0 w1_0_0 dW0_0_0 = a1
  try generalize Gen.adjloop_general_11_f_d1_63026597406b f f_d1 f_d2 g g_d1 g_d2 t0 dt theta y0_0_0 w0_0_0 w1_0_0 dW0_0_0 = a2
  try generalize Gen.adjloop_general_11_f_d1_ba36ce1aa217 f f_d1 f_d2 g g_d1 g_d2 t0 dt theta y0_0_0 w0_0_0 w1_0_0 dW0_0_0 = a3
  try generalize Gen.adjloop_general_11_f_d2_2c059cfea197 f f_d1 f_d2 g g_d1 g_d2 t0 dt theta y0_0_0 w0_0_0 w1_0_0 dW0_0_0 = a4
  try generalize Gen.adjloop_general_11_f_d2_3e3107e3480f f f_d1 f_d2 g g_d1 g_d2 t0 dt theta y0_0_0 w0_0_0 w1_0_0 dW0_0_0 = a5
  try generalize Gen.adjloop_general_11_f_d2_68a32c836609 f f_d1 f_d2 g g_d1 g_d2 t0 dt theta y0_0_0 w0_0_0 w1_0_0 dW0_0_0 = a6
  try generalize Gen.adjloop_general_11_g_32efc6e6b11b f f_d1 f_d2 g g_d1 g_d2 t0 dt theta y0_0_0 w0_0_0 w1_0_0 dW0_0_0 = a7
  try generalize Gen.adjloop_general_11_g_7f3fa59e2935 f f_d1 f_d2 g g_d1 g_d2 t0 dt theta y0_0_0 w0_0_0 w1_0_0 dW0_0_0 = a8
  try generalize Gen.adjloop_general_11_g_d1_706495d03ff0 f f_d1 f_d2 g g_d1 g_d2 t0 dt theta y0_0_0 w0_0_0 w1_0_0 dW0_0_0 = a9
  try generalize Gen.adjloop_general_11_g_d1_72076cb18aa5 f f_d1 f_d2 g g_d1 g_d2 t0 dt theta y0_0_0 w0_0_0 w1_0_0 dW0_0_0 = a10
  try generalize Gen.adjloop_general_11_g_d2_4a27075d754d f f_d1 f_d2 g g_d1 g_d2 t0 dt theta y0_0_0 w0_0_0 w1_0_0 dW0_0_0 = a11
  try generalize Gen.adjloop_general_11_g_d2_c69034bf7027 f f_d1 f_d2 g g_d1 g_d2 t0 dt theta y0_0_0 w0_0_0 w1_0_0 dW0_0_0 = a12
  try generalize Gen.adjloop_general_11_g_d2_ddcc3b2c1fd3 f f_d1 f_d2 g g_d1 g_d2 t0 dt theta y0_0_0 w0_0_0 w1_0_0 dW0_0_0 = a13
  try (first | ring | (field_simp; ring))

set_option maxHeartbeats 4000000 in
/-- `adjloop_scalar_11`: `fw_0_0_0` = `pl_0_0_0` -/
theorem adjloop_scalar_11_fw_0_0_0 (f : K → K → K → K) (f_d1 : K → K → K → K) (f_d2 : K → K → K → K) (g : K → K → K → K) (g_d1 : K → K → K → K) (g_d2 : K → K → K → K) (t0 dt theta y0_0_0 w0_0_0 w1_0_0 dW0_0_0 : K) (hdt : dt ≠ 0) :
    Gen.adjloop_scalar_11_fw_0_0_0 f f_d1 f_d2 g g_d1 g_d2 t0 dt theta y0_0_0 w0_0_0 w1_0_0 dW0_0_0 = Gen.adjloop_scalar_11_pl_0_0_0 f f_d1 f_d2 g g_d1 g_d2 t0 dt theta y0_0_0 w0_0_0 w1_0_0 dW0_0_0 := by
  have e1 : t0 + 0 * dt + dt = t0 + 1 * dt := by ring
  have e2 : -(t0 + 1 * dt) + dt = -(t0 + 0 * dt) := by ring
  have e3 : -(t0 + 0 * dt) - -(t0 + 1 * dt) = dt := by ring
  have e4 : t0 + 1 * dt - (t0 + 0 * dt) = dt := by ring
  simp only [Gen.adjloop_scalar_11_fw_0_0_0, Gen.adjloop_scalar_11_pl_0_0_0, neg_neg, e1, e2, min_self, e3, e4]
  try (first | ring | (field_simp; ring))

set_option maxHeartbeats 4000000 in
/-- `adjloop_scalar_11`: `fw_1_0_0` = `pl_1_0_0` -/
theorem adjloop_scalar_11_fw_1_0_0 (f : K → K → K → K) (f_d1 : K → K → K → K) (f_d2 : K → K → K → K) (g : K → K → K → K) (g_d1 : K → K → K → K) (g_d2 : K → K → K → K) (t0 dt theta y0_0_0 w0_0_0 w1_0_0 dW0_0_0 : K) (hdt : dt ≠ 0) :
    Gen.adjloop_scalar_11_fw_1_0_0 f f_d1 f_d2 g g_d1 g_d2 t0 dt theta y0_0_0 w0_0_0 w1_0_0 dW0_0_0 = Gen.adjloop_scalar_11_pl_1_0_0 f f_d1 f_d2 g g_d1 g_d2 t0 dt theta y0_0_0 w0_0_0 w1_0_0 dW0_0_0 := by
  have e1 : t0 + 0 * dt + dt = t0 + 1 * dt := by ring
  have e2 : -(t0 + 1 * dt) + dt = -(t0 + 0 * dt) := by ring
  have e3 : -(t0 + 0 * dt) - -(t0 + 1 * dt) = dt := by ring
  have e4 : t0 + 1 * dt - (t0 + 0 * dt) = dt := by ring
  simp only [Gen.adjloop_scalar_11_fw_1_0_0, Gen.adjloop_scalar_11_pl_1_0_0, neg_neg, e1, e2, min_self, e3, e4]
  try (first | ring | (field_simp; ring))

set_option maxHeartbeats 4000000 in
/-- `adjloop_scalar_11`: `ad_y_0_0` = `bp_y_0_0` -/
theorem adjloop_scalar_11_ad_y_0_0 (f : K → K → K → K) (f_d1 : K → K → K → K) (f_d2 : K → K → K → K) (g : K → K → K → K) (g_d1 : K → K → K → K) (g_d2 : K → K → K → K) (t0 dt theta y0_0_0 w0_0_0 w1_0_0 dW0_0_0 : K) (hdt : dt ≠ 0) :
    Gen.adjloop_scalar_11_ad_y_0_0 f f_d1 f_d2 g g_d1 g_d2 t0 dt theta y0_0_0 w0_0_0 w1_0_0 dW0_0_0 = Gen.adjloop_scalar_11_bp_y_0_0 f f_d1 f_d2 g g_d1 g_d2 t0 dt theta y0_0_0 w0_0_0 w1_0_0 dW0_0_0 := by
  have e1 : t0 + 0 * dt + dt = t0 + 1 * dt := by ring
  have e2 : -(t0 + 1 * dt) + dt = -(t0 + 0 * dt) := by ring
  have e3 : -(t0 + 0 * dt) - -(t0 + 1 * dt) = dt := by ring
  have e4 : t0 + 1 * dt - (t0 + 0 * dt) = dt := by ring
  simp only [Gen.adjloop_scalar_11_ad_y_0_0, Gen.adjloop_scalar_11_bp_y_0_0, neg_neg, e1, e2, min_self, e3, e4]
  rw [show Gen.adjloop_scalar_11_f_d1_ba36ce1aa217 f f_d1 f_d2 g g_d1 g_d2 t0 dt theta y0_0_0 w0_0_0 w1_0_0 dW0_0_0 = Gen.adjloop_scalar_11_f_d1_63026597406b f f_d1 f_d2 g g_d1 g_d2 t0 dt theta y0_0_0 w0_0_0 w1_0_0 dW0_0_0 from by simp only [Gen.adjloop_scalar_11_f_d1_ba36ce1aa217, Gen.adjloop_scalar_11_f_d1_63026597406b, e1, e2, min_self]]
  rw [show Gen.adjloop_scalar_11_g_d1_72076cb18aa5 f f_d1 f_d2 g g_d1 g_d2 t0 dt theta y0_0_0 w0_0_0 w1_0_0 dW0_0_0 = Gen.adjloop_scalar_11_g_d1_706495d03ff0 f f_d1 f_d2 g g_d1 g_d2 t0 dt theta y0_0_0 w0_0_0 w1_0_0 dW0_0_0 from by simp only [Gen.adjloop_scalar_11_g_d1_72076cb18aa5, Gen.adjloop_scalar_11_g_d1_706495d03ff0, e1, e2, min_self]]
  try generalize Gen.adjloop_scalar_11_f_4460654369b4 f f_d1 f_d2 g g_d1 g_d2 t0 dt theta y0_0_0 w0_0_0 w1_0_0 dW0_0_0 = a0
  try generalize Gen.adjloop_scalar_11_f_b9b7574b1b5e f f_d1 f_d2 g g_d1 g_d2 t0 dt theta y0_0_0 w0_0_0 w1_0_0 dW0_0_0 = a1
  try generalize Gen.adjloop_scalar_11_f_d1_21b622e4cb05 f f_d1 f_d2 g g_d1 g_d2 t0 dt theta y0_0_0 w0_0_0 w1_0_0 dW0_0_0 = a2
  try generalize Gen.adjloop_scalar_11_f_d1_63026597406b f f_d1 f_d2 g g_d1 g_d2 t0 dt theta y0_0_0 w0_0_0 w1_0_0 dW0_0_0 = a3
  try generalize Gen.adjloop_scalar_11_f_d1_ba36ce1aa217 f f_d1 f_d2 g g_d1 g_d2 t0 dt theta y0_0_0 w0_0_0 w1_0_0 dW0_0_0 = a4
  try generalize Gen.adjloop_scalar_11_g_32efc6e6b11b f f_d1 f_d2 g g_d1 g_d2 t0 dt theta y0_0_0 w0_0_0 w1_0_0 dW0_0_0 = a5
  try generalize Gen.adjloop_scalar_11_g_7f3fa59e2935 f f_d1 f_d2 g g_d1 g_d2 t0 dt theta y0_0_0 w0_0_0 w1_0_0 dW0_0_0 = a6
  try generalize Gen.adjloop_scalar_11_g_d1_706495d03ff0 f f_d1 f_d2 g g_d1 g_d2 t0 dt theta y0_0_0 w0_0_0 w1_0_0 dW0_0_0 = a7
  try generalize Gen.adjloop_scalar_11_g_d1_72076cb18aa5 f f_d1 f_d2 g g_d1 g_d2 t0 dt theta y0_0_0 w0_0_0 w1_0_0 dW0_0_0 = a8
  try generalize Gen.adjloop_scalar_11_g_d1_a9716afbb519 f f_d1 f_d2 g g_d1 g_d2 t0 dt theta y0_0_0 w0_0_0 w1_0_0 dW0_0_0 = a9
  try (first | ring | (field_simp; ring))

set_option maxHeartbeats 4000000 in
/-- `adjloop_scalar_11`: `ad_th` = `bp_th` -/
theorem adjloop_scalar_11_ad_th (f : K → K → K → K) (f_d1 : K → K → K → K) (f_d2 : K → K → K → K) (g : K → K → K → K) (g_d1 : K → K → K → K) (g_d2 : K → K → K → K) (t0 dt theta y0_0_0 w0_0_0 w1_0_0 dW0_0_0 : K) (hdt : dt ≠ 0) :
    Gen.adjloop_scalar_11_ad_th f f_d1 f_d2 g g_d1 g_d2 t0 dt theta y0_0_0 w0_0_0 w1_0_0 dW0_0_0 = Gen.adjloop_scalar_11_bp_th f f_d1 f_d2 g g_d1 g_d2 t0 dt theta y0_0_0 w0_0_0 w1_0_0 dW0_0_0 := by
  have e1 : t0 + 0 * dt + dt = t0 + 1 * dt := by ring
  have e2 : -(t0 + 1 * dt) + dt = -(t0 + 0 * dt) := by ring
  have e3 : -(t0 + 0 * dt) - -(t0 + 1 * dt) = dt := by ring
  have e4 : t0 + 1 * dt - (t0 + 0 * dt) = dt := by ring
  simp only [Gen.adjloop_scalar_11_ad_th, Gen.adjloop_scalar_11_bp_th, neg_neg, e1, e2, min_self, e3, e4]
  rw [show Gen.adjloop_scalar_11_f_d1_ba36ce1aa217 f f_d1 f_d2 g g_d1 g_d2 t0 dt theta y0_0_0 w0_0_0 w1_0_0 dW0_0_0 = Gen.adjloop_scalar_11_f_d1_63026597406b f f_d1 f_d2 g g_d1 g_d2 t0 dt theta y0_0_0 w0_0_0 w1_0_0 dW0_0_0 from by simp only [Gen.adjloop_scalar_11_f_d1_ba36ce1aa217, Gen.adjloop_scalar_11_f_d1_63026597406b, e1, e2, min_self]]
  rw [show Gen.adjloop_scalar_11_f_d2_68a32c836609 f f_d1 f_d2 g g_d1 g_d2 t0 dt theta y0_0_0 w0_0_0 w1_0_0 dW0_0_0 = Gen.adjloop_scalar_11_f_d2_2c059cfea197 f f_d1 f_d2 g g_d1 g_d2 t0 dt theta y0_0_0 w0_0_0 w1_0_0 dW0_0_0 from by simp only [Gen.adjloop_scalar_11_f_d2_68a32c836609, Gen.adjloop_scalar_11_f_d2_2c059cfea197, e1, e2, min_self]]
  rw [show Gen.adjloop_scalar_11_g_d1_72076cb18aa5 f f_d1 f_d2 g g_d1 g_d2 t0 dt theta y0_0_0 w0_0_0 w1_0_0 dW0_0_0 = Gen.adjloop_scalar_11_g_d1_706495d03ff0 f f_d1 f_d2 g g_d1 g_d2 t0 dt theta y0_0_0 w0_0_0 w1_0_0 dW0_0_0 from by simp only [Gen.adjloop_scalar_11_g_d1_72076cb18aa5, Gen.adjloop_scalar_11_g_d1_706495d03ff0, e1, e2, min_self]]
  rw [show Gen.adjloop_scalar_11_g_d2_c69034bf7027 f f_d1 f_d2 g g_d1 g_d2 t0 dt theta y0_0_0 w0_0_0 w1_0_0 dW0_0_0 = Gen.adjloop_scalar_11_g_d2_4a27075d754d f f_d1 f_d2 g g_d1 g_d2 t0 dt theta y0_0_0 w0_0_0 w1_0_0 dW0_0_0 from by simp only [Gen.adjloop_scalar_11_g_d2_c69034bf7027, Gen.adjloop_scalar_11_g_d2_4a27075d754d, e1, e2, min_self]]
  try generalize Gen.adjloop_scalar_11_f_4460654369b4 f f_d1 f_d2 g g_d1 g_d2 t0 dt theta y0_0_0 w0_0_0 w1_0_0 dW0_0_0 = a0
  try generalize Gen.adjloop_scalar_11_f_b9b7574b1b5e f f_d1 f_d2 g g_d1 g_d2 t0 dt theta y0_0_0 w0_0_0 w1_0_0 dW0_0_0 = a1
  try generalize Gen.adjloop_scalar_11_f_d1_63026597406b f f_d1 f_d2 g g_d1 g_d2 t0 dt theta y0_0_0 w0_0_0 w1_0_0 dW0_0_0 = a2
  try generalize Gen.adjloop_scalar_11_f_d1_ba36ce1aa217 f f_d1 f_d2 g g_d1 g_d2 t0 dt theta y0_0_0 w0_0_0 w1_0_0 dW0_0_0 = a3
  try generalize Gen.adjloop_scalar_11_f_d2_2c059cfea197 f f_d1 f_d2 g g_d1 g_d2 t0 dt theta y0_0_0 w0_0_0 w1_0_0 dW0_0_0 = a4
  try generalize Gen.adjloop_scalar_11_f_d2_3e3107e3480f f f_d1 f_d2 g g_d1 g_d2 t0 dt theta y0_0_0 w0_0_0 w1_0_0 dW0_0_0 = a5
  try generalize Gen.adjloop_scalar_11_f_d2_68a32c836609 f f_d1 f_d2 g g_d1 g_d2 t0 dt theta y0_0_0 w0_0_0 w1_0_0 dW0_0_0 = a6
  try generalize Gen.adjloop_scalar_11_g_32efc6e6b11b f f_d1 f_d2 g g_d1 g_d2 t0 dt theta y0_0_0 w0_0_0 w1_0_0 dW0_0_0 = a7
  try generalize Gen.adjloop_scalar_11_g_7f3fa59e2935 f f_d1 f_d2 g g_d1 g_d2 t0 dt theta y0_0_0 w0_0_0 w1_0_0 dW0_0_0 = a8
  try generalize Gen.adjloop_scalar_11_g_d1_706495d03ff0 f f_d1 f_d2 g g_d1 g_d2 t0 dt theta y0_0_0 w0_0_0 w1_0_0 dW0_0_0 = a9
  try generalize Gen.adjloop_scalar_11_g_d1_72076cb18aa5 f f_d1 f_d2 g g_d1 g_d2 t0 dt theta y0_0_0 w0_0_0 w1_0_0 dW0_0_0 = a10
  try generalize Gen.adjloop_scalar_11_g_d2_4a27075d754d f f_d1 f_d2 g g_d1 g_d2 t0 dt theta y0_0_0 w0_0_0 w1_0_0 dW0_0_0 = a11
  try generalize Gen.adjloop_scalar_11_g_d2_c69034bf7027 f f_d1 f_d2 g g_d1 g_d2 t0 dt theta y0_0_0 w0_0_0 w1_0_0 dW0_0_0 = a12
  try generalize Gen.adjloop_scalar_11_g_d2_ddcc3b2c1fd3 f f_d1 f_d2 g g_d1 g_d2 t0 dt theta y0_0_0 w0_0_0 w1_0_0 dW0_0_0 = a13
  try (first | ring | (field_simp; ring))

set_option maxHeartbeats 4000000 in
/-- `adjloop_additive_11`: `fw_0_0_0` = `pl_0_0_0` -/
theorem adjloop_additive_11_fw_0_0_0 (f : K → K → K → K) (f_d1 : K → K → K → K) (f_d2 : K → K → K → K) (g : K → K → K) (g_d1 : K → K → K) (t0 dt theta y0_0_0 w0_0_0 w1_0_0 dW0_0_0 : K) (hdt : dt ≠ 0) :
    Gen.adjloop_additive_11_fw_0_0_0 f f_d1 f_d2 g g_d1 t0 dt theta y0_0_0 w0_0_0 w1_0_0 dW0_0_0 = Gen.adjloop_additive_11_pl_0_0_0 f f_d1 f_d2 g g_d1 t0 dt theta y0_0_0 w0_0_0 w1_0_0 dW0_0_0 := by
  have e1 : t0 + 0 * dt + dt = t0 + 1 * dt := by ring
  have e2 : -(t0 + 1 * dt) + dt = -(t0 + 0 * dt) := by ring
  have e3 : -(t0 + 0 * dt) - -(t0 + 1 * dt) = dt := by ring
  have e4 : t0 + 1 * dt - (t0 + 0 * dt) = dt := by ring
  simp only [Gen.adjloop_additive_11_fw_0_0_0, Gen.adjloop_additive_11_pl_0_0_0, neg_neg, e1, e2, min_self, e3, e4]
  try (first | ring | (field_simp; ring))

set_option maxHeartbeats 4000000 in
/-- `adjloop_additive_11`: `fw_1_0_0` = `pl_1_0_0` -/
theorem adjloop_additive_11_fw_1_0_0 (f : K → K → K → K) (f_d1 : K → K → K → K) (f_d2 : K → K → K → K) (g : K → K → K) (g_d1 : K → K → K) (t0 dt theta y0_0_0 w0_0_0 w1_0_0 dW0_0_0 : K) (hdt : dt ≠ 0) :
    Gen.adjloop_additive_11_fw_1_0_0 f f_d1 f_d2 g g_d1 t0 dt theta y0_0_0 w0_0_0 w1_0_0 dW0_0_0 = Gen.adjloop_additive_11_pl_1_0_0 f f_d1 f_d2 g g_d1 t0 dt theta y0_0_0 w0_0_0 w1_0_0 dW0_0_0 := by
  have e1 : t0 + 0 * dt + dt = t0 + 1 * dt := by ring
  have e2 : -(t0 + 1 * dt) + dt = -(t0 + 0 * dt) := by ring
  have e3 : -(t0 + 0 * dt) - -(t0 + 1 * dt) = dt := by ring
  have e4 : t0 + 1 * dt - (t0 + 0 * dt) = dt := by ring
  simp only [Gen.adjloop_additive_11_fw_1_0_0, Gen.adjloop_additive_11_pl_1_0_0, neg_neg, e1, e2, min_self, e3, e4]
  try (first | ring | (field_simp; ring))

set_option maxHeartbeats 4000000 in
/-- `adjloop_additive_11`: `ad_y_0_0` = `bp_y_0_0` -/
theorem adjloop_additive_11_ad_y_0_0 (f : K → K → K → K) (f_d1 : K → K → K → K) (f_d2 : K → K → K → K) (g : K → K → K) (g_d1 : K → K → K) (t0 dt theta y0_0_0 w0_0_0 w1_0_0 dW0_0_0 : K) (hdt : dt ≠ 0) :
    Gen.adjloop_additive_11_ad_y_0_0 f f_d1 f_d2 g g_d1 t0 dt theta y0_0_0 w0_0_0 w1_0_0 dW0_0_0 = Gen.adjloop_additive_11_bp_y_0_0 f f_d1 f_d2 g g_d1 t0 dt theta y0_0_0 w0_0_0 w1_0_0 dW0_0_0 := by
  have e1 : t0 + 0 * dt + dt = t0 + 1 * dt := by ring
  have e2 : -(t0 + 1 * dt) + dt = -(t0 + 0 * dt) := by ring
  have e3 : -(t0 + 0 * dt) - -(t0 + 1 * dt) = dt := by ring
  have e4 : t0 + 1 * dt - (t0 + 0 * dt) = dt := by ring
  simp only [Gen.adjloop_additive_11_ad_y_0_0, Gen.adjloop_additive_11_bp_y_0_0, neg_neg, e1, e2, min_self, e3, e4]
  rw [show Gen.adjloop_additive_11_f_d1_d87523244c8e f f_d1 f_d2 g g_d1 t0 dt theta y0_0_0 w0_0_0 w1_0_0 dW0_0_0 = Gen.adjloop_additive_11_f_d1_20b522cc8b3a f f_d1 f_d2 g g_d1 t0 dt theta y0_0_0 w0_0_0 w1_0_0 dW0_0_0 from by simp only [Gen.adjloop_additive_11_f_d1_d87523244c8e, Gen.adjloop_additive_11_f_d1_20b522cc8b3a, e1, e2, min_self]]
  try generalize Gen.adjloop_additive_11_f_0a3108df94d9 f f_d1 f_d2 g g_d1 t0 dt theta y0_0_0 w0_0_0 w1_0_0 dW0_0_0 = a0
  try generalize Gen.adjloop_additive_11_f_b9b7574b1b5e f f_d1 f_d2 g g_d1 t0 dt theta y0_0_0 w0_0_0 w1_0_0 dW0_0_0 = a1
  try generalize Gen.adjloop_additive_11_f_d1_20b522cc8b3a f f_d1 f_d2 g g_d1 t0 dt theta y0_0_0 w0_0_0 w1_0_0 dW0_0_0 = a2
  try generalize Gen.adjloop_additive_11_f_d1_21b622e4cb05 f f_d1 f_d2 g g_d1 t0 dt theta y0_0_0 w0_0_0 w1_0_0 dW0_0_0 = a3
  try generalize Gen.adjloop_additive_11_f_d1_d87523244c8e f f_d1 f_d2 g g_d1 t0 dt theta y0_0_0 w0_0_0 w1_0_0 dW0_0_0 = a4
  try generalize Gen.adjloop_additive_11_g_e2d32220cc7e f f_d1 f_d2 g g_d1 t0 dt theta y0_0_0 w0_0_0 w1_0_0 dW0_0_0 = a5
  try (first | ring | (field_simp; ring))

set_option maxHeartbeats 4000000 in
/-- `adjloop_additive_11`: `ad_th` = `bp_th` -/
theorem adjloop_additive_11_ad_th (f : K → K → K → K) (f_d1 : K → K → K → K) (f_d2 : K → K → K → K) (g : K → K → K) (g_d1 : K → K → K) (t0 dt theta y0_0_0 w0_0_0 w1_0_0 dW0_0_0 : K) (hdt : dt ≠ 0) :
    Gen.adjloop_additive_11_ad_th f f_d1 f_d2 g g_d1 t0 dt theta y0_0_0 w0_0_0 w1_0_0 dW0_0_0 = Gen.adjloop_additive_11_bp_th f f_d1 f_d2 g g_d1 t0 dt theta y0_0_0 w0_0_0 w1_0_0 dW0_0_0 := by
  have e1 : t0 + 0 * dt + dt = t0 + 1 * dt := by ring
  have e2 : -(t0 + 1 * dt) + dt = -(t0 + 0 * dt) := by ring
  have e3 : -(t0 + 0 * dt) - -(t0 + 1 * dt) = dt := by ring
  have e4 : t0 + 1 * dt - (t0 + 0 * dt) = dt := by ring
  simp only [Gen.adjloop_additive_11_ad_th, Gen.adjloop_additive_11_bp_th, neg_neg, e1, e2, min_self, e3, e4]
  rw [show Gen.adjloop_additive_11_f_d1_d87523244c8e f f_d1 f_d2 g g_d1 t0 dt theta y0_0_0 w0_0_0 w1_0_0 dW0_0_0 = Gen.adjloop_additive_11_f_d1_20b522cc8b3a f f_d1 f_d2 g g_d1 t0 dt theta y0_0_0 w0_0_0 w1_0_0 dW0_0_0 from by simp only [Gen.adjloop_additive_11_f_d1_d87523244c8e, Gen.adjloop_additive_11_f_d1_20b522cc8b3a, e1, e2, min_self]]
  rw [show Gen.adjloop_additive_11_f_d2_f2b0099fb107 f f_d1 f_d2 g g_d1 t0 dt theta y0_0_0 w0_0_0 w1_0_0 dW0_0_0 = Gen.adjloop_additive_11_f_d2_7af21862133f f f_d1 f_d2 g g_d1 t0 dt theta y0_0_0 w0_0_0 w1_0_0 dW0_0_0 from by simp only [Gen.adjloop_additive_11_f_d2_f2b0099fb107, Gen.adjloop_additive_11_f_d2_7af21862133f, e1, e2, min_self]]
  rw [show Gen.adjloop_additive_11_g_d1_bc9919eabf36 f f_d1 f_d2 g g_d1 t0 dt theta y0_0_0 w0_0_0 w1_0_0 dW0_0_0 = Gen.adjloop_additive_11_g_d1_6096fcabb2e0 f f_d1 f_d2 g g_d1 t0 dt theta y0_0_0 w0_0_0 w1_0_0 dW0_0_0 from by simp only [Gen.adjloop_additive_11_g_d1_bc9919eabf36, Gen.adjloop_additive_11_g_d1_6096fcabb2e0, e1, e2, min_self]]
  try generalize Gen.adjloop_additive_11_f_0a3108df94d9 f f_d1 f_d2 g g_d1 t0 dt theta y0_0_0 w0_0_0 w1_0_0 dW0_0_0 = a0
  try generalize Gen.adjloop_additive_11_f_b9b7574b1b5e f f_d1 f_d2 g g_d1 t0 dt theta y0_0_0 w0_0_0 w1_0_0 dW0_0_0 = a1
  try generalize Gen.adjloop_additive_11_f_d1_20b522cc8b3a f f_d1 f_d2 g g_d1 t0 dt theta y0_0_0 w0_0_0 w1_0_0 dW0_0_0 = a2
  try generalize Gen.adjloop_additive_11_f_d1_d87523244c8e f f_d1 f_d2 g g_d1 t0 dt theta y0_0_0 w0_0_0 w1_0_0 dW0_0_0 = a3
  try generalize Gen.adjloop_additive_11_f_d2_3e3107e3480f f f_d1 f_d2 g g_d1 t0 dt theta y0_0_0 w0_0_0 w1_0_0 dW0_0_0 = a4
  try generalize Gen.adjloop_additive_11_f_d2_7af21862133f f f_d1 f_d2 g g_d1 t0 dt theta y0_0_0 w0_0_0 w1_0_0 dW0_0_0 = a5
  try generalize Gen.adjloop_additive_11_f_d2_f2b0099fb107 f f_d1 f_d2 g g_d1 t0 dt theta y0_0_0 w0_0_0 w1_0_0 dW0_0_0 = a6
  try generalize Gen.adjloop_additive_11_g_b3cb31f1b4dd f f_d1 f_d2 g g_d1 t0 dt theta y0_0_0 w0_0_0 w1_0_0 dW0_0_0 = a7
  try generalize Gen.adjloop_additive_11_g_d1_6096fcabb2e0 f f_d1 f_d2 g g_d1 t0 dt theta y0_0_0 w0_0_0 w1_0_0 dW0_0_0 = a8
  try generalize Gen.adjloop_additive_11_g_d1_a6d471722b26 f f_d1 f_d2 g g_d1 t0 dt theta y0_0_0 w0_0_0 w1_0_0 dW0_0_0 = a9
  try generalize Gen.adjloop_additive_11_g_d1_bc9919eabf36 f f_d1 f_d2 g g_d1 t0 dt theta y0_0_0 w0_0_0 w1_0_0 dW0_0_0 = a10
  try generalize Gen.adjloop_additive_11_g_e2d32220cc7e f f_d1 f_d2 g g_d1 t0 dt theta y0_0_0 w0_0_0 w1_0_0 dW0_0_0 = a11
  try (first | ring | (field_simp; ring))

set_option maxHeartbeats 4000000 in
/-- `adjloop_general_22`: `fw_0_0_0` = `pl_0_0_0` -/
theorem adjloop_general_22_fw_0_0_0 (f0 : K → K → K → K → K) (f0_d1 : K → K → K → K → K) (f0_d2 : K → K → K → K → K) (f0_d3 : K → K → K → K → K) (f1 : K → K → K → K → K) (f1_d1 : K → K → K → K → K) (f1_d2 : K → K → K → K → K) (f1_d3 : K → K → K → K → K) (g00 : K → K → K → K → K) (g00_d1 : K → K → K → K → K) (g00_d2 : K → K → K → K → K) (g00_d3 : K → K → K → K → K) (g01 : K → K → K → K → K) (g01_d1 : K → K → K → K → K) (g01_d2 : K → K → K → K → K) (g01_d3 : K → K → K → K → K) (g10 : K → K → K → K → K) (g10_d1 : K → K → K → K → K) (g10_d2 : K → K → K → K → K) (g10_d3 : K → K → K → K → K) (g11 : K → K → K → K → K) (g11_d1 : K → K → K → K → K) (g11_d2 : K → K → K → K → K) (g11_d3 : K → K → K → K → K) (t0 dt theta y0_0_0 y0_0_1 w0_0_0 w0_0_1 w1_0_0 w1_0_1 dW0_0_0 dW0_0_1 : K) (hdt : dt ≠ 0) :
    Gen.adjloop_general_22_fw_0_0_0 f0 f0_d1 f0_d2 f0_d3 f1 f1_d1 f1_d2 f1_d3 g00 g00_d1 g00_d2 g00_d3 g01 g01_d1 g01_d2 g01_d3 g10 g10_d1 g10_d2 g10_d3 g11 g11_d1 g11_d2 g11_d3 t0 dt theta y0_0_0 y0_0_1 w0_0_0 w0_0_1 w1_0_0 w1_0_1 dW0_0_0 dW0_0_1 = Gen.adjloop_general_22_pl_0_0_0 f0 f0_d1 f0_d2 f0_d3 f1 f1_d1 f1_d2 f1_d3 g00 g00_d1 g00_d2 g00_d3 g01 g01_d1 g01_d2 g01_d3 g10 g10_d1 g10_d2 g10_d3 g11 g11_d1 g11_d2 g11_d3 t0 dt theta y0_0_0 y0_0_1 w0_0_0 w0_0_1 w1_0_0 w1_0_1 dW0_0_0 dW0_0_1 := by
  have e1 : t0 + 0 * dt + dt = t0 + 1 * dt := by ring
  have e2 : -(t0 + 1 * dt) + dt = -(t0 + 0 * dt) := by ring
  have e3 : -(t0 + 0 * dt) - -(t0 + 1 * dt) = dt := by ring
  have e4 : t0 + 1 * dt - (t0 + 0 * dt) = dt := by ring
  simp only [Gen.adjloop_general_22_fw_0_0_0, Gen.adjloop_general_22_pl_0_0_0, neg_neg, e1, e2, min_self, e3, e4]
  try (first | ring | (field_simp; ring))

set_option maxHeartbeats 4000000 in
/-- `adjloop_general_22`: `fw_0_0_1` = `pl_0_0_1` -/
theorem adjloop_general_22_fw_0_0_1 (f0 : K → K → K → K → K) (f0_d1 : K → K → K → K → K) (f0_d2 : K → K → K → K → K) (f0_d3 : K → K → K → K → K) (f1 : K → K → K → K → K) (f1_d1 : K → K → K → K → K) (f1_d2 : K → K → K → K → K) (f1_d3 : K → K → K → K → K) (g00 : K → K → K → K → K) (g00_d1 : K → K → K → K → K) (g00_d2 : K → K → K → K → K) (g00_d3 : K → K → K → K → K) (g01 : K → K → K → K → K) (g01_d1 : K → K → K → K → K) (g01_d2 : K → K → K → K → K) (g01_d3 : K → K → K → K → K) (g10 : K → K → K → K → K) (g10_d1 : K → K → K → K → K) (g10_d2 : K → K → K → K → K) (g10_d3 : K → K → K → K → K) (g11 : K → K → K → K → K) (g11_d1 : K → K → K → K → K) (g11_d2 : K → K → K → K → K) (g11_d3 : K → K → K → K → K) (t0 dt theta y0_0_0 y0_0_1 w0_0_0 w0_0_1 w1_0_0 w1_0_1 dW0_0_0 dW0_0_1 : K) (hdt : dt ≠ 0) :
    Gen.adjloop_general_22_fw_0_0_1 f0 f0_d1 f0_d2 f0_d3 f1 f1_d1 f1_d2 f1_d3 g00 g00_d1 g00_d2 g00_d3 g01 g01_d1 g01_d2 g01_d3 g10 g10_d1 g10_d2 g10_d3 g11 g11_d1 g11_d2 g11_d3 t0 dt theta y0_0_0 y0_0_1 w0_0_0 w0_0_1 w1_0_0 w1_0_1 dW0_0_0 dW0_0_1 = Gen.adjloop_general_22_pl_0_0_1 f0 f0_d1 f0_d2 f0_d3 f1 f1_d1 f1_d2 f1_d3 g00 g00_d1 g00_d2 g00_d3 g01 g01_d1 g01_d2 g01_d3 g10 g10_d1 g10_d2 g10_d3 g11 g11_d1 g11_d2 g11_d3 t0 dt theta y0_0_0 y0_0_1 w0_0_0 w0_0_1 w1_0_0 w1_0_1 dW0_0_0 dW0_0_1 := by
  have e1 : t0 + 0 * dt + dt = t0 + 1 * dt := by ring
  have e2 : -(t0 + 1 * dt) + dt = -(t0 + 0 * dt) := by ring
  have e3 : -(t0 + 0 * dt) - -(t0 + 1 * dt) = dt := by ring
  have e4 : t0 + 1 * dt - (t0 + 0 * dt) = dt := by ring
  simp only [Gen.adjloop_general_22_fw_0_0_1, Gen.adjloop_general_22_pl_0_0_1, neg_neg, e1, e2, min_self, e3, e4]
  try (first | ring | (field_simp; ring))

set_option maxHeartbeats 4000000 in
/-- `adjloop_general_22`: `fw_1_0_0` = `pl_1_0_0` -/
theorem adjloop_general_22_fw_1_0_0 (f0 : K → K → K → K → K) (f0_d1 : K → K → K → K → K) (f0_d2 : K → K → K → K → K) (f0_d3 : K → K → K → K → K) (f1 : K → K → K → K → K) (f1_d1 : K → K → K → K → K) (f1_d2 : K → K → K → K → K) (f1_d3 : K → K → K → K → K) (g00 : K → K → K → K → K) (g00_d1 : K → K → K → K → K) (g00_d2 : K → K → K → K → K) (g00_d3 : K → K → K → K → K) (g01 : K → K → K → K → K) (g01_d1 : K → K → K → K → K) (g01_d2 : K → K → K → K → K) (g01_d3 : K → K → K → K → K) (g10 : K → K → K → K → K) (g10_d1 : K → K → K → K → K) (g10_d2 : K → K → K → K → K) (g10_d3 : K → K → K → K → K) (g11 : K → K → K → K → K) (g11_d1 : K → K → K → K → K) (g11_d2 : K → K → K → K → K) (g11_d3 : K → K → K → K → K) (t0 dt theta y0_0_0 y0_0_1 w0_0_0 w0_0_1 w1_0_0 w1_0_1 dW0_0_0 dW0_0_1 : K) (hdt : dt ≠ 0) :
    Gen.adjloop_general_22_fw_1_0_0 f0 f0_d1 f0_d2 f0_d3 f1 f1_d1 f1_d2 f1_d3 g00 g00_d1 g00_d2 g00_d3 g01 g01_d1 g01_d2 g01_d3 g10 g10_d1 g10_d2 g10_d3 g11 g11_d1 g11_d2 g11_d3 t0 dt theta y0_0_0 y0_0_1 w0_0_0 w0_0_1 w1_0_0 w1_0_1 dW0_0_0 dW0_0_1 = Gen.adjloop_general_22_pl_1_0_0 f0 f0_d1 f0_d2 f0_d3 f1 f1_d1 f1_d2 f1_d3 g00 g00_d1 g00_d2 g00_d3 g01 g01_d1 g01_d2 g01_d3 g10 g10_d1 g10_d2 g10_d3 g11 g11_d1 g11_d2 g11_d3 t0 dt theta y0_0_0 y0_0_1 w0_0_0 w0_0_1 w1_0_0 w1_0_1 dW0_0_0 dW0_0_1 := by
  have e1 : t0 + 0 * dt + dt = t0 + 1 * dt := by ring
  have e2 : -(t0 + 1 * dt) + dt = -(t0 + 0 * dt) := by ring
  have e3 : -(t0 + 0 * dt) - -(t0 + 1 * dt) = dt := by ring
  have e4 : t0 + 1 * dt - (t0 + 0 * dt) = dt := by ring
  simp only [Gen.adjloop_general_22_fw_1_0_0, Gen.adjloop_general_22_pl_1_0_0, neg_neg, e1, e2, min_self, e3, e4]
  try (first | ring | (field_simp; ring))

set_option maxHeartbeats 4000000 in
/-- `adjloop_general_22`: `fw_1_0_1` = `pl_1_0_1` -/
theorem adjloop_general_22_fw_1_0_1 (f0 : K → K → K → K → K) (f0_d1 : K → K → K → K → K) (f0_d2 : K → K → K → K → K) (f0_d3 : K → K → K → K → K) (f1 : K → K → K → K → K) (f1_d1 : K → K → K → K → K) (f1_d2 : K → K → K → K → K) (f1_d3 : K → K → K → K → K) (g00 : K → K → K → K → K) (g00_d1 : K → K → K → K → K) (g00_d2 : K → K → K → K → K) (g00_d3 : K → K → K → K → K) (g01 : K → K → K → K → K) (g01_d1 : K → K → K → K → K) (g01_d2 : K → K → K → K → K) (g01_d3 : K → K → K → K → K) (g10 : K → K → K → K → K) (g10_d1 : K → K → K → K → K) (g10_d2 : K → K → K → K → K) (g10_d3 : K → K → K → K → K) (g11 : K → K → K → K → K) (g11_d1 : K → K → K → K → K) (g11_d2 : K → K → K → K → K) (g11_d3 : K → K → K → K → K) (t0 dt theta y0_0_0 y0_0_1 w0_0_0 w0_0_1 w1_0_0 w1_0_1 dW0_0_0 dW0_0_1 : K) (hdt : dt ≠ 0) :
    Gen.adjloop_general_22_fw_1_0_1 f0 f0_d1 f0_d2 f0_d3 f1 f1_d1 f1_d2 f1_d3 g00 g00_d1 g00_d2 g00_d3 g01 g01_d1 g01_d2 g01_d3 g10 g10_d1 g10_d2 g10_d3 g11 g11_d1 g11_d2 g11_d3 t0 dt theta y0_0_0 y0_0_1 w0_0_0 w0_0_1 w1_0_0 w1_0_1 dW0_0_0 dW0_0_1 = Gen.adjloop_general_22_pl_1_0_1 f0 f0_d1 f0_d2 f0_d3 f1 f1_d1 f1_d2 f1_d3 g00 g00_d1 g00_d2 g00_d3 g01 g01_d1 g01_d2 g01_d3 g10 g10_d1 g10_d2 g10_d3 g11 g11_d1 g11_d2 g11_d3 t0 dt theta y0_0_0 y0_0_1 w0_0_0 w0_0_1 w1_0_0 w1_0_1 dW0_0_0 dW0_0_1 := by
  have e1 : t0 + 0 * dt + dt = t0 + 1 * dt := by ring
  have e2 : -(t0 + 1 * dt) + dt = -(t0 + 0 * dt) := by ring
  have e3 : -(t0 + 0 * dt) - -(t0 + 1 * dt) = dt := by ring
  have e4 : t0 + 1 * dt - (t0 + 0 * dt) = dt := by ring
  simp only [Gen.adjloop_general_22_fw_1_0_1, Gen.adjloop_general_22_pl_1_0_1, neg_neg, e1, e2, min_self, e3, e4]
  try (first | ring | (field_simp; ring))

set_option maxHeartbeats 4000000 in
/-- `adjloop_general_22`: `ad_y_0_0` = `bp_y_0_0` -/
theorem adjloop_general_22_ad_y_0_0 (f0 : K → K → K → K → K) (f0_d1 : K → K → K → K → K) (f0_d2 : K → K → K → K → K) (f0_d3 : K → K → K → K → K) (f1 : K → K → K → K → K) (f1_d1 : K → K → K → K → K) (f1_d2 : K → K → K → K → K) (f1_d3 : K → K → K → K → K) (g00 : K → K → K → K → K) (g00_d1 : K → K → K → K → K) (g00_d2 : K → K → K → K → K) (g00_d3 : K → K → K → K → K) (g01 : K → K → K → K → K) (g01_d1 : K → K → K → K → K) (g01_d2 : K → K → K → K → K) (g01_d3 : K → K → K → K → K) (g10 : K → K → K → K → K) (g10_d1 : K → K → K → K → K) (g10_d2 : K → K → K → K → K) (g10_d3 : K → K → K → K → K) (g11 : K → K → K → K → K) (g11_d1 : K → K → K → K → K) (g11_d2 : K → K → K → K → K) (g11_d3 : K → K → K → K → K) (t0 dt theta y0_0_0 y0_0_1 w0_0_0 w0_0_1 w1_0_0 w1_0_1 dW0_0_0 dW0_0_1 : K) (hdt : dt ≠ 0) :
    Gen.adjloop_general_22_ad_y_0_0 f0 f0_d1 f0_d2 f0_d3 f1 f1_d1 f1_d2 f1_d3 g00 g00_d1 g00_d2 g00_d3 g01 g01_d1 g01_d2 g01_d3 g10 g10_d1 g10_d2 g10_d3 g11 g11_d1 g11_d2 g11_d3 t0 dt theta y0_0_0 y0_0_1 w0_0_0 w0_0_1 w1_0_0 w1_0_1 dW0_0_0 dW0_0_1 = Gen.adjloop_general_22_bp_y_0_0 f0 f0_d1 f0_d2 f0_d3 f1 f1_d1 f1_d2 f1_d3 g00 g00_d1 g00_d2 g00_d3 g01 g01_d1 g01_d2 g01_d3 g10 g10_d1 g10_d2 g10_d3 g11 g11_d1 g11_d2 g11_d3 t0 dt theta y0_0_0 y0_0_1 w0_0_0 w0_0_1 w1_0_0 w1_0_1 dW0_0_0 dW0_0_1 := by
  have e1 : t0 + 0 * dt + dt = t0 + 1 * dt := by ring
  have e2 : -(t0 + 1 * dt) + dt = -(t0 + 0 * dt) := by ring
  have e3 : -(t0 + 0 * dt) - -(t0 + 1 * dt) = dt := by ring
  have e4 : t0 + 1 * dt - (t0 + 0 * dt) = dt := by ring
  simp only [Gen.adjloop_general_22_ad_y_0_0, Gen.adjloop_general_22_bp_y_0_0, neg_neg, e1, e2, min_self, e3, e4]
  rw [show Gen.adjloop_general_22_f0_d1_94e757153f17 f0 f0_d1 f0_d2 f0_d3 f1 f1_d1 f1_d2 f1_d3 g00 g00_d1 g00_d2 g00_d3 g01 g01_d1 g01_d2 g01_d3 g10 g10_d1 g10_d2 g10_d3 g11 g11_d1 g11_d2 g11_d3 t0 dt theta y0_0_0 y0_0_1 w0_0_0 w0_0_1 w1_0_0 w1_0_1 dW0_0_0 dW0_0_1 = Gen.adjloop_general_22_f0_d1_15634f09b6d9 f0 f0_d1 f0_d2 f0_d3 f1 f1_d1 f1_d2 f1_d3 g00 g00_d1 g00_d2 g00_d3 g01 g01_d1 g01_d2 g01_d3 g10 g10_d1 g10_d2 g10_d3 g11 g11_d1 g11_d2 g11_d3 t0 dt theta y0_0_0 y0_0_1 w0_0_0 w0_0_1 w1_0_0 w1_0_1 dW0_0_0 dW0_0_1 from by simp only [Gen.adjloop_general_22_f0_d1_94e757153f17, Gen.adjloop_general_22_f0_d1_15634f09b6d9, e1, e2, min_self]]
  rw [show Gen.adjloop_general_22_f0_d2_7d71de1c3128 f0 f0_d1 f0_d2 f0_d3 f1 f1_d1 f1_d2 f1_d3 g00 g00_d1 g00_d2 g00_d3 g01 g01_d1 g01_d2 g01_d3 g10 g10_d1 g10_d2 g10_d3 g11 g11_d1 g11_d2 g11_d3 t0 dt theta y0_0_0 y0_0_1 w0_0_0 w0_0_1 w1_0_0 w1_0_1 dW0_0_0 dW0_0_1 = Gen.adjloop_general_22_f0_d2_7c4c0451e7db f0 f0_d1 f0_d2 f0_d3 f1 f1_d1 f1_d2 f1_d3 g00 g00_d1 g00_d2 g00_d3 g01 g01_d1 g01_d2 g01_d3 g10 g10_d1 g10_d2 g10_d3 g11 g11_d1 g11_d2 g11_d3 t0 dt theta y0_0_0 y0_0_1 w0_0_0 w0_0_1 w1_0_0 w1_0_1 dW0_0_0 dW0_0_1 from by simp only [Gen.adjloop_general_22_f0_d2_7d71de1c3128, Gen.adjloop_general_22_f0_d2_7c4c0451e7db, e1, e2, min_self]]
  rw [show Gen.adjloop_general_22_f1_d1_e3739d2f150a f0 f0_d1 f0_d2 f0_d3 f1 f1_d1 f1_d2 f1_d3 g00 g00_d1 g00_d2 g00_d3 g01 g01_d1 g01_d2 g01_d3 g10 g10_d1 g10_d2 g10_d3 g11 g11_d1 g11_d2 g11_d3 t0 dt theta y0_0_0 y0_0_1 w0_0_0 w0_0_1 w1_0_0 w1_0_1 dW0_0_0 dW0_0_1 = Gen.adjloop_general_22_f1_d1_d0ac0737681b f0 f0_d1 f0_d2 f0_d3 f1 f1_d1 f1_d2 f1_d3 g00 g00_d1 g00_d2 g00_d3 g01 g01_d1 g01_d2 g01_d3 g10 g10_d1 g10_d2 g10_d3 g11 g11_d1 g11_d2 g11_d3 t0 dt theta y0_0_0 y0_0_1 w0_0_0 w0_0_1 w1_0_0 w1_0_1 dW0_0_0 dW0_0_1 from by simp only [Gen.adjloop_general_22_f1_d1_e3739d2f150a, Gen.adjloop_general_22_f1_d1_d0ac0737681b, e1, e2, min_self]]
  rw [show Gen.adjloop_general_22_f1_d2_ff5e7643cd13 f0 f0_d1 f0_d2 f0_d3 f1 f1_d1 f1_d2 f1_d3 g00 g00_d1 g00_d2 g00_d3 g01 g01_d1 g01_d2 g01_d3 g10 g10_d1 g10_d2 g10_d3 g11 g11_d1 g11_d2 g11_d3 t0 dt theta y0_0_0 y0_0_1 w0_0_0 w0_0_1 w1_0_0 w1_0_1 dW0_0_0 dW0_0_1 = Gen.adjloop_general_22_f1_d2_43511aa619c2 f0 f0_d1 f0_d2 f0_d3 f1 f1_d1 f1_d2 f1_d3 g00 g00_d1 g00_d2 g00_d3 g01 g01_d1 g01_d2 g01_d3 g10 g10_d1 g10_d2 g10_d3 g11 g11_d1 g11_d2 g11_d3 t0 dt theta y0_0_0 y0_0_1 w0_0_0 w0_0_1 w1_0_0 w1_0_1 dW0_0_0 dW0_0_1 from by simp only [Gen.adjloop_general_22_f1_d2_ff5e7643cd13, Gen.adjloop_general_22_f1_d2_43511aa619c2, e1, e2, min_self]]
  rw [show Gen.adjloop_general_22_g00_d1_fb59be7d66fa f0 f0_d1 f0_d2 f0_d3 f1 f1_d1 f1_d2 f1_d3 g00 g00_d1 g00_d2 g00_d3 g01 g01_d1 g01_d2 g01_d3 g10 g10_d1 g10_d2 g10_d3 g11 g11_d1 g11_d2 g11_d3 t0 dt theta y0_0_0 y0_0_1 w0_0_0 w0_0_1 w1_0_0 w1_0_1 dW0_0_0 dW0_0_1 = Gen.adjloop_general_22_g00_d1_0e0ed7f41a61 f0 f0_d1 f0_d2 f0_d3 f1 f1_d1 f1_d2 f1_d3 g00 g00_d1 g00_d2 g00_d3 g01 g01_d1 g01_d2 g01_d3 g10 g10_d1 g10_d2 g10_d3 g11 g11_d1 g11_d2 g11_d3 t0 dt theta y0_0_0 y0_0_1 w0_0_0 w0_0_1 w1_0_0 w1_0_1 dW0_0_0 dW0_0_1 from by simp only [Gen.adjloop_general_22_g00_d1_fb59be7d66fa, Gen.adjloop_general_22_g00_d1_0e0ed7f41a61, e1, e2, min_self]]
  rw [show Gen.adjloop_general_22_g00_d2_e26ff264c485 f0 f0_d1 f0_d2 f0_d3 f1 f1_d1 f1_d2 f1_d3 g00 g00_d1 g00_d2 g00_d3 g01 g01_d1 g01_d2 g01_d3 g10 g10_d1 g10_d2 g10_d3 g11 g11_d1 g11_d2 g11_d3 t0 dt theta y0_0_0 y0_0_1 w0_0_0 w0_0_1 w1_0_0 w1_0_1 dW0_0_0 dW0_0_1 = Gen.adjloop_general_22_g00_d2_292668480761 f0 f0_d1 f0_d2 f0_d3 f1 f1_d1 f1_d2 f1_d3 g00 g00_d1 g00_d2 g00_d3 g01 g01_d1 g01_d2 g01_d3 g10 g10_d1 g10_d2 g10_d3 g11 g11_d1 g11_d2 g11_d3 t0 dt theta y0_0_0 y0_0_1 w0_0_0 w0_0_1 w1_0_0 w1_0_1 dW0_0_0 dW0_0_1 from by simp only [Gen.adjloop_general_22_g00_d2_e26ff264c485, Gen.adjloop_general_22_g00_d2_292668480761, e1, e2, min_self]]
  rw [show Gen.adjloop_general_22_g01_d1_91fbfbc93063 f0 f0_d1 f0_d2 f0_d3 f1 f1_d1 f1_d2 f1_d3 g00 g00_d1 g00_d2 g00_d3 g01 g01_d1 g01_d2 g01_d3 g10 g10_d1 g10_d2 g10_d3 g11 g11_d1 g11_d2 g11_d3 t0 dt theta y0_0_0 y0_0_1 w0_0_0 w0_0_1 w1_0_0 w1_0_1 dW0_0_0 dW0_0_1 = Gen.adjloop_general_22_g01_d1_004f124a13cb f0 f0_d1 f0_d2 f0_d3 f1 f1_d1 f1_d2 f1_d3 g00 g00_d1 g00_d2 g00_d3 g01 g01_d1 g01_d2 g01_d3 g10 g10_d1 g10_d2 g10_d3 g11 g11_d1 g11_d2 g11_d3 t0 dt theta y0_0_0 y0_0_1 w0_0_0 w0_0_1 w1_0_0 w1_0_1 dW0_0_0 dW0_0_1 from by simp only [Gen.adjloop_general_22_g01_d1_91fbfbc93063, Gen.adjloop_general_22_g01_d1_004f124a13cb, e1, e2, min_self]]
  rw [show Gen.adjloop_general_22_g01_d2_d4258cf3199e f0 f0_d1 f0_d2 f0_d3 f1 f1_d1 f1_d2 f1_d3 g00 g00_d1 g00_d2 g00_d3 g01 g01_d1 g01_d2 g01_d3 g10 g10_d1 g10_d2 g10_d3 g11 g11_d1 g11_d2 g11_d3 t0 dt theta y0_0_0 y0_0_1 w0_0_0 w0_0_1 w1_0_0 w1_0_1 dW0_0_0 dW0_0_1 = Gen.adjloop_general_22_g01_d2_6aaf1b3e33ff f0 f0_d1 f0_d2 f0_d3 f1 f1_d1 f1_d2 f1_d3 g00 g00_d1 g00_d2 g00_d3 g01 g01_d1 g01_d2 g01_d3 g10 g10_d1 g10_d2 g10_d3 g11 g11_d1 g11_d2 g11_d3 t0 dt theta y0_0_0 y0_0_1 w0_0_0 w0_0_1 w1_0_0 w1_0_1 dW0_0_0 dW0_0_1 from by simp only [Gen.adjloop_general_22_g01_d2_d4258cf3199e, Gen.adjloop_general_22_g01_d2_6aaf1b3e33ff, e1, e2, min_self]]
  rw [show Gen.adjloop_general_22_g10_d1_c8bb79da411e f0 f0_d1 f0_d2 f0_d3 f1 f1_d1 f1_d2 f1_d3 g00 g00_d1 g00_d2 g00_d3 g01 g01_d1 g01_d2 g01_d3 g10 g10_d1 g10_d2 g10_d3 g11 g11_d1 g11_d2 g11_d3 t0 dt theta y0_0_0 y0_0_1 w0_0_0 w0_0_1 w1_0_0 w1_0_1 dW0_0_0 dW0_0_1 = Gen.adjloop_general_22_g10_d1_1c1cb23786a4 f0 f0_d1 f0_d2 f0_d3 f1 f1_d1 f1_d2 f1_d3 g00 g00_d1 g00_d2 g00_d3 g01 g01_d1 g01_d2 g01_d3 g10 g10_d1 g10_d2 g10_d3 g11 g11_d1 g11_d2 g11_d3 t0 dt theta y0_0_0 y0_0_1 w0_0_0 w0_0_1 w1_0_0 w1_0_1 dW0_0_0 dW0_0_1 from by simp only [Gen.adjloop_general_22_g10_d1_c8bb79da411e, Gen.adjloop_general_22_g10_d1_1c1cb23786a4, e1, e2, min_self]]
  rw [show Gen.adjloop_general_22_g10_d2_34a16b053e26 f0 f0_d1 f0_d2 f0_d3 f1 f1_d1 f1_d2 f1_d3 g00 g00_d1 g00_d2 g00_d3 g01 g01_d1 g01_d2 g01_d3 g10 g10_d1 g10_d2 g10_d3 g11 g11_d1 g11_d2 g11_d3 t0 dt theta y0_0_0 y0_0_1 w0_0_0 w0_0_1 w1_0_0 w1_0_1 dW0_0_0 dW0_0_1 = Gen.adjloop_general_22_g10_d2_25a870ea714f f0 f0_d1 f0_d2 f0_d3 f1 f1_d1 f1_d2 f1_d3 g00 g00_d1 g00_d2 g00_d3 g01 g01_d1 g01_d2 g01_d3 g10 g10_d1 g10_d2 g10_d3 g11 g11_d1 g11_d2 g11_d3 t0 dt theta y0_0_0 y0_0_1 w0_0_0 w0_0_1 w1_0_0 w1_0_1 dW0_0_0 dW0_0_1 from by simp only [Gen.adjloop_general_22_g10_d2_34a16b053e26, Gen.adjloop_general_22_g10_d2_25a870ea714f, e1, e2, min_self]]
  rw [show Gen.adjloop_general_22_g11_d1_9c3c31565422 f0 f0_d1 f0_d2 f0_d3 f1 f1_d1 f1_d2 f1_d3 g00 g00_d1 g00_d2 g00_d3 g01 g01_d1 g01_d2 g01_d3 g10 g10_d1 g10_d2 g10_d3 g11 g11_d1 g11_d2 g11_d3 t0 dt theta y0_0_0 y0_0_1 w0_0_0 w0_0_1 w1_0_0 w1_0_1 dW0_0_0 dW0_0_1 = Gen.adjloop_general_22_g11_d1_9267b8cca483 f0 f0_d1 f0_d2 f0_d3 f1 f1_d1 f1_d2 f1_d3 g00 g00_d1 g00_d2 g00_d3 g01 g01_d1 g01_d2 g01_d3 g10 g10_d1 g10_d2 g10_d3 g11 g11_d1 g11_d2 g11_d3 t0 dt theta y0_0_0 y0_0_1 w0_0_0 w0_0_1 w1_0_0 w1_0_1 dW0_0_0 dW0_0_1 from by simp only [Gen.adjloop_general_22_g11_d1_9c3c31565422, Gen.adjloop_general_22_g11_d1_9267b8cca483, e1, e2, min_self]]
  rw [show Gen.adjloop_general_22_g11_d2_440c14275e3f f0 f0_d1 f0_d2 f0_d3 f1 f1_d1 f1_d2 f1_d3 g00 g00_d1 g00_d2 g00_d3 g01 g01_d1 g01_d2 g01_d3 g10 g10_d1 g10_d2 g10_d3 g11 g11_d1 g11_d2 g11_d3 t0 dt theta y0_0_0 y0_0_1 w0_0_0 w0_0_1 w1_0_0 w1_0_1 dW0_0_0 dW0_0_1 = Gen.adjloop_general_22_g11_d2_42fcf1b050b9 f0 f0_d1 f0_d2 f0_d3 f1 f1_d1 f1_d2 f1_d3 g00 g00_d1 g00_d2 g00_d3 g01 g01_d1 g01_d2 g01_d3 g10 g10_d1 g10_d2 g10_d3 g11 g11_d1 g11_d2 g11_d3 t0 dt theta y0_0_0 y0_0_1 w0_0_0 w0_0_1 w1_0_0 w1_0_1 dW0_0_0 dW0_0_1 from by simp only [Gen.adjloop_general_22_g11_d2_440c14275e3f, Gen.adjloop_general_22_g11_d2_42fcf1b050b9, e1, e2, min_self]]
  try generalize Gen.adjloop_general_22_f0_458d0b220324 f0 f0_d1 f0_d2 f0_d3 f1 f1_d1 f1_d2 f1_d3 g00 g00_d1 g00_d2 g00_d3 g01 g01_d1 g01_d2 g01_d3 g10 g10_d1 g10_d2 g10_d3 g11 g11_d1 g11_d2 g11_d3 t0 dt theta y0_0_0 y0_0_1 w0_0_0 w0_0_1 w1_0_0 w1_0_1 dW0_0_0 dW0_0_1 = a0
  try generalize Gen.adjloop_general_22_f0_8b7b27059830 f0 f0_d1 f0_d2 f0_d3 f1 f1_d1 f1_d2 f1_d3 g00 g00_d1 g00_d2 g00_d3 g01 g01_d1 g01_d2 g01_d3 g10 g10_d1 g10_d2 g10_d3 g11 g11_d1 g11_d2 g11_d3 t0 dt theta y0_0_0 y0_0_1 w0_0_0 w0_0_1 w1_0_0 w1_0_1 dW0_0_0 dW0_0_1 = a1
  try generalize Gen.adjloop_general_22_f0_d1_15634f09b6d9 f0 f0_d1 f0_d2 f0_d3 f1 f1_d1 f1_d2 f1_d3 g00 g00_d1 g00_d2 g00_d3 g01 g01_d1 g01_d2 g01_d3 g10 g10_d1 g10_d2 g10_d3 g11 g11_d1 g11_d2 g11_d3 t0 dt theta y0_0_0 y0_0_1 w0_0_0 w0_0_1 w1_0_0 w1_0_1 dW0_0_0 dW0_0_1 = a2
  try generalize Gen.adjloop_general_22_f0_d1_94e757153f17 f0 f0_d1 f0_d2 f0_d3 f1 f1_d1 f1_d2 f1_d3 g00 g00_d1 g00_d2 g00_d3 g01 g01_d1 g01_d2 g01_d3 g10 g10_d1 g10_d2 g10_d3 g11 g11_d1 g11_d2 g11_d3 t0 dt theta y0_0_0 y0_0_1 w0_0_0 w0_0_1 w1_0_0 w1_0_1 dW0_0_0 dW0_0_1 = a3
  try generalize Gen.adjloop_general_22_f0_d1_fb0e9b55dee2 f0 f0_d1 f0_d2 f0_d3 f1 f1_d1 f1_d2 f1_d3 g00 g00_d1 g00_d2 g00_d3 g01 g01_d1 g01_d2 g01_d3 g10 g10_d1 g10_d2 g10_d3 g11 g11_d1 g11_d2 g11_d3 t0 dt theta y0_0_0 y0_0_1 w0_0_0 w0_0_1 w1_0_0 w1_0_1 dW0_0_0 dW0_0_1 = a4
  try generalize Gen.adjloop_general_22_f0_d2_7c4c0451e7db f0 f0_d1 f0_d2 f0_d3 f1 f1_d1 f1_d2 f1_d3 g00 g00_d1 g00_d2 g00_d3 g01 g01_d1 g01_d2 g01_d3 g10 g10_d1 g10_d2 g10_d3 g11 g11_d1 g11_d2 g11_d3 t0 dt theta y0_0_0 y0_0_1 w0_0_0 w0_0_1 w1_0_0 w1_0_1 dW0_0_0 dW0_0_1 = a5
  try generalize Gen.adjloop_general_22_f0_d2_7d71de1c3128 f0 f0_d1 f0_d2 f0_d3 f1 f1_d1 f1_d2 f1_d3 g00 g00_d1 g00_d2 g00_d3 g01 g01_d1 g01_d2 g01_d3 g10 g10_d1 g10_d2 g10_d3 g11 g11_d1 g11_d2 g11_d3 t0 dt theta y0_0_0 y0_0_1 w0_0_0 w0_0_1 w1_0_0 w1_0_1 dW0_0_0 dW0_0_1 = a6
  try generalize Gen.adjloop_general_22_f1_17941926937e f0 f0_d1 f0_d2 f0_d3 f1 f1_d1 f1_d2 f1_d3 g00 g00_d1 g00_d2 g00_d3 g01 g01_d1 g01_d2 g01_d3 g10 g10_d1 g10_d2 g10_d3 g11 g11_d1 g11_d2 g11_d3 t0 dt theta y0_0_0 y0_0_1 w0_0_0 w0_0_1 w1_0_0 w1_0_1 dW0_0_0 dW0_0_1 = a7
  try generalize Gen.adjloop_general_22_f1_7c0be7f7fbb3 f0 f0_d1 f0_d2 f0_d3 f1 f1_d1 f1_d2 f1_d3 g00 g00_d1 g00_d2 g00_d3 g01 g01_d1 g01_d2 g01_d3 g10 g10_d1 g10_d2 g10_d3 g11 g11_d1 g11_d2 g11_d3 t0 dt theta y0_0_0 y0_0_1 w0_0_0 w0_0_1 w1_0_0 w1_0_1 dW0_0_0 dW0_0_1 = a8
  try generalize Gen.adjloop_general_22_f1_d1_47e9fbc94c3d f0 f0_d1 f0_d2 f0_d3 f1 f1_d1 f1_d2 f1_d3 g00 g00_d1 g00_d2 g00_d3 g01 g01_d1 g01_d2 g01_d3 g10 g10_d1 g10_d2 g10_d3 g11 g11_d1 g11_d2 g11_d3 t0 dt theta y0_0_0 y0_0_1 w0_0_0 w0_0_1 w1_0_0 w1_0_1 dW0_0_0 dW0_0_1 = a9
  try generalize Gen.adjloop_general_22_f1_d1_d0ac0737681b f0 f0_d1 f0_d2 f0_d3 f1 f1_d1 f1_d2 f1_d3 g00 g00_d1 g00_d2 g00_d3 g01 g01_d1 g01_d2 g01_d3 g10 g10_d1 g10_d2 g10_d3 g11 g11_d1 g11_d2 g11_d3 t0 dt theta y0_0_0 y0_0_1 w0_0_0 w0_0_1 w1_0_0 w1_0_1 dW0_0_0 dW0_0_1 = a10
  try generalize Gen.adjloop_general_22_f1_d1_e3739d2f150a f0 f0_d1 f0_d2 f0_d3 f1 f1_d1 f1_d2 f1_d3 g00 g00_d1 g00_d2 g00_d3 g01 g01_d1 g01_d2 g01_d3 g10 g10_d1 g10_d2 g10_d3 g11 g11_d1 g11_d2 g11_d3 t0 dt theta y0_0_0 y0_0_1 w0_0_0 w0_0_1 w1_0_0 w1_0_1 dW0_0_0 dW0_0_1 = a11
  try generalize Gen.adjloop_general_22_f1_d2_43511aa619c2 f0 f0_d1 f0_d2 f0_d3 f1 f1_d1 f1_d2 f1_d3 g00 g00_d1 g00_d2 g00_d3 g01 g01_d1 g01_d2 g01_d3 g10 g10_d1 g10_d2 g10_d3 g11 g11_d1 g11_d2 g11_d3 t0 dt theta y0_0_0 y0_0_1 w0_0_0 w0_0_1 w1_0_0 w1_0_1 dW0_0_0 dW0_0_1 = a12
  try generalize Gen.adjloop_general_22_f1_d2_ff5e7643cd13 f0 f0_d1 f0_d2 f0_d3 f1 f1_d1 f1_d2 f1_d3 g00 g00_d1 g00_d2 g00_d3 g01 g01_d1 g01_d2 g01_d3 g10 g10_d1 g10_d2 g10_d3 g11 g11_d1 g11_d2 g11_d3 t0 dt theta y0_0_0 y0_0_1 w0_0_0 w0_0_1 w1_0_0 w1_0_1 dW0_0_0 dW0_0_1 = a13
  try generalize Gen.adjloop_general_22_g00_462e2db3a013 f0 f0_d1 f0_d2 f0_d3 f1 f1_d1 f1_d2 f1_d3 g00 g00_d1 g00_d2 g00_d3 g01 g01_d1 g01_d2 g01_d3 g10 g10_d1 g10_d2 g10_d3 g11 g11_d1 g11_d2 g11_d3 t0 dt theta y0_0_0 y0_0_1 w0_0_0 w0_0_1 w1_0_0 w1_0_1 dW0_0_0 dW0_0_1 = a14
  try generalize Gen.adjloop_general_22_g00_9e18be45a5ce f0 f0_d1 f0_d2 f0_d3 f1 f1_d1 f1_d2 f1_d3 g00 g00_d1 g00_d2 g00_d3 g01 g01_d1 g01_d2 g01_d3 g10 g10_d1 g10_d2 g10_d3 g11 g11_d1 g11_d2 g11_d3 t0 dt theta y0_0_0 y0_0_1 w0_0_0 w0_0_1 w1_0_0 w1_0_1 dW0_0_0 dW0_0_1 = a15
  try generalize Gen.adjloop_general_22_g00_d1_0e0ed7f41a61 f0 f0_d1 f0_d2 f0_d3 f1 f1_d1 f1_d2 f1_d3 g00 g00_d1 g00_d2 g00_d3 g01 g01_d1 g01_d2 g01_d3 g10 g10_d1 g10_d2 g10_d3 g11 g11_d1 g11_d2 g11_d3 t0 dt theta y0_0_0 y0_0_1 w0_0_0 w0_0_1 w1_0_0 w1_0_1 dW0_0_0 dW0_0_1 = a16
  try generalize Gen.adjloop_general_22_g00_d1_60729d945828 f0 f0_d1 f0_d2 f0_d3 f1 f1_d1 f1_d2 f1_d3 g00 g00_d1 g00_d2 g00_d3 g01 g01_d1 g01_d2 g01_d3 g10 g10_d1 g10_d2 g10_d3 g11 g11_d1 g11_d2 g11_d3 t0 dt theta y0_0_0 y0_0_1 w0_0_0 w0_0_1 w1_0_0 w1_0_1 dW0_0_0 dW0_0_1 = a17
  try generalize Gen.adjloop_general_22_g00_d1_fb59be7d66fa f0 f0_d1 f0_d2 f0_d3 f1 f1_d1 f1_d2 f1_d3 g00 g00_d1 g00_d2 g00_d3 g01 g01_d1 g01_d2 g01_d3 g10 g10_d1 g10_d2 g10_d3 g11 g11_d1 g11_d2 g11_d3 t0 dt theta y0_0_0 y0_0_1 w0_0_0 w0_0_1 w1_0_0 w1_0_1 dW0_0_0 dW0_0_1 = a18
  try generalize Gen.adjloop_general_22_g00_d2_292668480761 f0 f0_d1 f0_d2 f0_d3 f1 f1_d1 f1_d2 f1_d3 g00 g00_d1 g00_d2 g00_d3 g01 g01_d1 g01_d2 g01_d3 g10 g10_d1 g10_d2 g10_d3 g11 g11_d1 g11_d2 g11_d3 t0 dt theta y0_0_0 y0_0_1 w0_0_0 w0_0_1 w1_0_0 w1_0_1 dW0_0_0 dW0_0_1 = a19
  try generalize Gen.adjloop_general_22_g00_d2_e26ff264c485 f0 f0_d1 f0_d2 f0_d3 f1 f1_d1 f1_d2 f1_d3 g00 g00_d1 g00_d2 g00_d3 g01 g01_d1 g01_d2 g01_d3 g10 g10_d1 g10_d2 g10_d3 g11 g11_d1 g11_d2 g11_d3 t0 dt theta y0_0_0 y0_0_1 w0_0_0 w0_0_1 w1_0_0 w1_0_1 dW0_0_0 dW0_0_1 = a20
  try generalize Gen.adjloop_general_22_g01_8f73612fb0d7 f0 f0_d1 f0_d2 f0_d3 f1 f1_d1 f1_d2 f1_d3 g00 g00_d1 g00_d2 g00_d3 g01 g01_d1 g01_d2 g01_d3 g10 g10_d1 g10_d2 g10_d3 g11 g11_d1 g11_d2 g11_d3 t0 dt theta y0_0_0 y0_0_1 w0_0_0 w0_0_1 w1_0_0 w1_0_1 dW0_0_0 dW0_0_1 = a21
  try generalize Gen.adjloop_general_22_g01_b8238ff245ae f0 f0_d1 f0_d2 f0_d3 f1 f1_d1 f1_d2 f1_d3 g00 g00_d1 g00_d2 g00_d3 g01 g01_d1 g01_d2 g01_d3 g10 g10_d1 g10_d2 g10_d3 g11 g11_d1 g11_d2 g11_d3 t0 dt theta y0_0_0 y0_0_1 w0_0_0 w0_0_1 w1_0_0 w1_0_1 dW0_0_0 dW0_0_1 = a22
  try generalize Gen.adjloop_general_22_g01_d1_004f124a13cb f0 f0_d1 f0_d2 f0_d3 f1 f1_d1 f1_d2 f1_d3 g00 g00_d1 g00_d2 g00_d3 g01 g01_d1 g01_d2 g01_d3 g10 g10_d1 g10_d2 g10_d3 g11 g11_d1 g11_d2 g11_d3 t0 dt theta y0_0_0 y0_0_1 w0_0_0 w0_0_1 w1_0_0 w1_0_1 dW0_0_0 dW0_0_1 = a23
  try generalize Gen.adjloop_general_22_g01_d1_3fcbb3ff0360 f0 f0_d1 f0_d2 f0_d3 f1 f1_d1 f1_d2 f1_d3 g00 g00_d1 g00_d2 g00_d3 g01 g01_d1 g01_d2 g01_d3 g10 g10_d1 g10_d2 g10_d3 g11 g11_d1 g11_d2 g11_d3 t0 dt theta y0_0_0 y0_0_1 w0_0_0 w0_0_1 w1_0_0 w1_0_1 dW0_0_0 dW0_0_1 = a24
  try generalize Gen.adjloop_general_22_g01_d1_91fbfbc93063 f0 f0_d1 f0_d2 f0_d3 f1 f1_d1 f1_d2 f1_d3 g00 g00_d1 g00_d2 g00_d3 g01 g01_d1 g01_d2 g01_d3 g10 g10_d1 g10_d2 g10_d3 g11 g11_d1 g11_d2 g11_d3 t0 dt theta y0_0_0 y0_0_1 w0_0_0 w0_0_1 w1_0_0 w1_0_1 dW0_0_0 dW0_0_1 = a25
  try generalize Gen.adjloop_general_22_g01_d2_6aaf1b3e33ff f0 f0_d1 f0_d2 f0_d3 f1 f1_d1 f1_d2 f1_d3 g00 g00_d1 g00_d2 g00_d3 g01 g01_d1 g01_d2 g01_d3 g10 g10_d1 g10_d2 g10_d3 g11 g11_d1 g11_d2 g11_d3 t0 dt theta y0_0_0 y0_0_1 w0_0_0 w0_0_1 w1_0_0 w1_0_1 dW0_0_0 dW0_0_1 = a26
  try generalize Gen.adjloop_general_22_g01_d2_d4258cf3199e f0 f0_d1 f0_d2 f0_d3 f1 f1_d1 f1_d2 f1_d3 g00 g00_d1 g00_d2 g00_d3 g01 g01_d1 g01_d2 g01_d3 g10 g10_d1 g10_d2 g10_d3 g11 g11_d1 g11_d2 g11_d3 t0 dt theta y0_0_0 y0_0_1 w0_0_0 w0_0_1 w1_0_0 w1_0_1 dW0_0_0 dW0_0_1 = a27
  try generalize Gen.adjloop_general_22_g10_cc8ea48e41b6 f0 f0_d1 f0_d2 f0_d3 f1 f1_d1 f1_d2 f1_d3 g00 g00_d1 g00_d2 g00_d3 g01 g01_d1 g01_d2 g01_d3 g10 g10_d1 g10_d2 g10_d3 g11 g11_d1 g11_d2 g11_d3 t0 dt theta y0_0_0 y0_0_1 w0_0_0 w0_0_1 w1_0_0 w1_0_1 dW0_0_0 dW0_0_1 = a28
  try generalize Gen.adjloop_general_22_g10_d1_1c1cb23786a4 f0 f0_d1 f0_d2 f0_d3 f1 f1_d1 f1_d2 f1_d3 g00 g00_d1 g00_d2 g00_d3 g01 g01_d1 g01_d2 g01_d3 g10 g10_d1 g10_d2 g10_d3 g11 g11_d1 g11_d2 g11_d3 t0 dt theta y0_0_0 y0_0_1 w0_0_0 w0_0_1 w1_0_0 w1_0_1 dW0_0_0 dW0_0_1 = a29
  try generalize Gen.adjloop_general_22_g10_d1_9f0854cdb16d f0 f0_d1 f0_d2 f0_d3 f1 f1_d1 f1_d2 f1_d3 g00 g00_d1 g00_d2 g00_d3 g01 g01_d1 g01_d2 g01_d3 g10 g10_d1 g10_d2 g10_d3 g11 g11_d1 g11_d2 g11_d3 t0 dt theta y0_0_0 y0_0_1 w0_0_0 w0_0_1 w1_0_0 w1_0_1 dW0_0_0 dW0_0_1 = a30
  try generalize Gen.adjloop_general_22_g10_d1_c8bb79da411e f0 f0_d1 f0_d2 f0_d3 f1 f1_d1 f1_d2 f1_d3 g00 g00_d1 g00_d2 g00_d3 g01 g01_d1 g01_d2 g01_d3 g10 g10_d1 g10_d2 g10_d3 g11 g11_d1 g11_d2 g11_d3 t0 dt theta y0_0_0 y0_0_1 w0_0_0 w0_0_1 w1_0_0 w1_0_1 dW0_0_0 dW0_0_1 = a31
  try generalize Gen.adjloop_general_22_g10_d2_25a870ea714f f0 f0_d1 f0_d2 f0_d3 f1 f1_d1 f1_d2 f1_d3 g00 g00_d1 g00_d2 g00_d3 g01 g01_d1 g01_d2 g01_d3 g10 g10_d1 g10_d2 g10_d3 g11 g11_d1 g11_d2 g11_d3 t0 dt theta y0_0_0 y0_0_1 w0_0_0 w0_0_1 w1_0_0 w1_0_1 dW0_0_0 dW0_0_1 = a32
  try generalize Gen.adjloop_general_22_g10_d2_34a16b053e26 f0 f0_d1 f0_d2 f0_d3 f1 f1_d1 f1_d2 f1_d3 g00 g00_d1 g00_d2 g00_d3 g01 g01_d1 g01_d2 g01_d3 g10 g10_d1 g10_d2 g10_d3 g11 g11_d1 g11_d2 g11_d3 t0 dt theta y0_0_0 y0_0_1 w0_0_0 w0_0_1 w1_0_0 w1_0_1 dW0_0_0 dW0_0_1 = a33
  try generalize Gen.adjloop_general_22_g10_dd89bcb9088f f0 f0_d1 f0_d2 f0_d3 f1 f1_d1 f1_d2 f1_d3 g00 g00_d1 g00_d2 g00_d3 g01 g01_d1 g01_d2 g01_d3 g10 g10_d1 g10_d2 g10_d3 g11 g11_d1 g11_d2 g11_d3 t0 dt theta y0_0_0 y0_0_1 w0_0_0 w0_0_1 w1_0_0 w1_0_1 dW0_0_0 dW0_0_1 = a34
  try generalize Gen.adjloop_general_22_g11_0908a869832b f0 f0_d1 f0_d2 f0_d3 f1 f1_d1 f1_d2 f1_d3 g00 g00_d1 g00_d2 g00_d3 g01 g01_d1 g01_d2 g01_d3 g10 g10_d1 g10_d2 g10_d3 g11 g11_d1 g11_d2 g11_d3 t0 dt theta y0_0_0 y0_0_1 w0_0_0 w0_0_1 w1_0_0 w1_0_1 dW0_0_0 dW0_0_1 = a35
  try generalize Gen.adjloop_general_22_g11_7674affb00fc f0 f0_d1 f0_d2 f0_d3 f1 f1_d1 f1_d2 f1_d3 g00 g00_d1 g00_d2 g00_d3 g01 g01_d1 g01_d2 g01_d3 g10 g10_d1 g10_d2 g10_d3 g11 g11_d1 g11_d2 g11_d3 t0 dt theta y0_0_0 y0_0_1 w0_0_0 w0_0_1 w1_0_0 w1_0_1 dW0_0_0 dW0_0_1 = a36
  try generalize Gen.adjloop_general_22_g11_d1_9267b8cca483 f0 f0_d1 f0_d2 f0_d3 f1 f1_d1 f1_d2 f1_d3 g00 g00_d1 g00_d2 g00_d3 g01 g01_d1 g01_d2 g01_d3 g10 g10_d1 g10_d2 g10_d3 g11 g11_d1 g11_d2 g11_d3 t0 dt theta y0_0_0 y0_0_1 w0_0_0 w0_0_1 w1_0_0 w1_0_1 dW0_0_0 dW0_0_1 = a37
  try generalize Gen.adjloop_general_22_g11_d1_9c3c31565422 f0 f0_d1 f0_d2 f0_d3 f1 f1_d1 f1_d2 f1_d3 g00 g00_d1 g00_d2 g00_d3 g01 g01_d1 g01_d2 g01_d3 g10 g10_d1 g10_d2 g10_d3 g11 g11_d1 g11_d2 g11_d3 t0 dt theta y0_0_0 y0_0_1 w0_0_0 w0_0_1 w1_0_0 w1_0_1 dW0_0_0 dW0_0_1 = a38
  try generalize Gen.adjloop_general_22_g11_d1_f181d4cb7b5c f0 f0_d1 f0_d2 f0_d3 f1 f1_d1 f1_d2 f1_d3 g00 g00_d1 g00_d2 g00_d3 g01 g01_d1 g01_d2 g01_d3 g10 g10_d1 g10_d2 g10_d3 g11 g11_d1 g11_d2 g11_d3 t0 dt theta y0_0_0 y0_0_1 w0_0_0 w0_0_1 w1_0_0 w1_0_1 dW0_0_0 dW0_0_1 = a39
  try generalize Gen.adjloop_general_22_g11_d2_42fcf1b050b9 f0 f0_d1 f0_d2 f0_d3 f1 f1_d1 f1_d2 f1_d3 g00 g00_d1 g00_d2 g00_d3 g01 g01_d1 g01_d2 g01_d3 g10 g10_d1 g10_d2 g10_d3 g11 g11_d1 g11_d2 g11_d3 t0 dt theta y0_0_0 y0_0_1 w0_0_0 w0_0_1 w1_0_0 w1_0_1 dW0_0_0 dW0_0_1 = a40
  try generalize Gen.adjloop_general_22_g11_d2_440c14275e3f f0 f0_d1 f0_d2 f0_d3 f1 f1_d1 f1_d2 f1_d3 g00 g00_d1 g00_d2 g00_d3 g01 g01_d1 g01_d2 g01_d3 g10 g10_d1 g10_d2 g10_d3 g11 g11_d1 g11_d2 g11_d3 t0 dt theta y0_0_0 y0_0_1 w0_0_0 w0_0_1 w1_0_0 w1_0_1 dW0_0_0 dW0_0_1 = a41
  try (first | ring | (field_simp; ring))

set_option maxHeartbeats 4000000 in
/-- `adjloop_general_22`: `ad_y_0_1` = `bp_y_0_1` -/
theorem adjloop_general_22_ad_y_0_1 (f0 : K → K → K → K → K) (f0_d1 : K → K → K → K → K) (f0_d2 : K → K → K → K → K) (f0_d3 : K → K → K → K → K) (f1 : K → K → K → K → K) (f1_d1 : K → K → K → K → K) (f1_d2 : K → K → K → K → K) (f1_d3 : K → K → K → K → K) (g00 : K → K → K → K → K) (g00_d1 : K → K → K → K → K) (g00_d2 : K → K → K → K → K) (g00_d3 : K → K → K → K → K) (g01 : K → K → K → K → K) (g01_d1 : K → K → K → K → K) (g01_d2 : K → K → K → K → K) (g01_d3 : K → K → K → K → K) (g10 : K → K → K → K → K) (g10_d1 : K → K → K → K → K) (g10_d2 : K → K → K → K → K) (g10_d3 : K → K → K → K → K) (g11 : K → K → K → K → K) (g11_d1 : K → K → K → K → K) (g11_d2 : K → K → K → K → K) (g11_d3 : K → K → K → K → K) (t0 dt theta y0_0_0 y0_0_1 w0_0_0 w0_0_1 w1_0_0 w1_0_1 dW0_0_0 dW0_0_1 : K) (hdt : dt ≠ 0) :
    Gen.adjloop_general_22_ad_y_0_1 f0 f0_d1 f0_d2 f0_d3 f1 f1_d1 f1_d2 f1_d3 g00 g00_d1 g00_d2 g00_d3 g01 g01_d1 g01_d2 g01_d3 g10 g10_d1 g10_d2 g10_d3 g11 g11_d1 g11_d2 g11_d3 t0 dt theta y0_0_0 y0_0_1 w0_0_0 w0_0_1 w1_0_0 w1_0_1 dW0_0_0 dW0_0_1 = Gen.adjloop_general_22_bp_y_0_1 f0 f0_d1 f0_d2 f0_d3 f1 f1_d1 f1_d2 f1_d3 g00 g00_d1 g00_d2 g00_d3 g01 g01_d1 g01_d2 g01_d3 g10 g10_d1 g10_d2 g10_d3 g11 g11_d1 g11_d2 g11_d3 t0 dt theta y0_0_0 y0_0_1 w0_0_0 w0_0_1 w1_0_0 w1_0_1 dW0_0_0 dW0_0_1 := by
  have e1 : t0 + 0 * dt + dt = t0 + 1 * dt := by ring
  have e2 : -(t0 + 1 * dt) + dt = -(t0 + 0 * dt) := by ring
  have e3 : -(t0 + 0 * dt) - -(t0 + 1 * dt) = dt := by ring
  have e4 : t0 + 1 * dt - (t0 + 0 * dt) = dt := by ring
  simp only [Gen.adjloop_general_22_ad_y_0_1, Gen.adjloop_general_22_bp_y_0_1, neg_neg, e1, e2, min_self, e3, e4]
  rw [show Gen.adjloop_general_22_f0_d1_94e757153f17 f0 f0_d1 f0_d2 f0_d3 f1 f1_d1 f1_d2 f1_d3 g00 g00_d1 g00_d2 g00_d3 g01 g01_d1 g01_d2 g01_d3 g10 g10_d1 g10_d2 g10_d3 g11 g11_d1 g11_d2 g11_d3 t0 dt theta y0_0_0 y0_0_1 w0_0_0 w0_0_1 w1_0_0 w1_0_1 dW0_0_0 dW0_0_1 = Gen.adjloop_general_22_f0_d1_15634f09b6d9 f0 f0_d1 f0_d2 f0_d3 f1 f1_d1 f1_d2 f1_d3 g00 g00_d1 g00_d2 g00_d3 g01 g01_d1 g01_d2 g01_d3 g10 g10_d1 g10_d2 g10_d3 g11 g11_d1 g11_d2 g11_d3 t0 dt theta y0_0_0 y0_0_1 w0_0_0 w0_0_1 w1_0_0 w1_0_1 dW0_0_0 dW0_0_1 from by simp only [Gen.adjloop_general_22_f0_d1_94e757153f17, Gen.adjloop_general_22_f0_d1_15634f09b6d9, e1, e2, min_self]]
  rw [show Gen.adjloop_general_22_f0_d2_7d71de1c3128 f0 f0_d1 f0_d2 f0_d3 f1 f1_d1 f1_d2 f1_d3 g00 g00_d1 g00_d2 g00_d3 g01 g01_d1 g01_d2 g01_d3 g10 g10_d1 g10_d2 g10_d3 g11 g11_d1 g11_d2 g11_d3 t0 dt theta y0_0_0 y0_0_1 w0_0_0 w0_0_1 w1_0_0 w1_0_1 dW0_0_0 dW0_0_1 = Gen.adjloop_general_22_f0_d2_7c4c0451e7db f0 f0_d1 f0_d2 f0_d3 f1 f1_d1 f1_d2 f1_d3 g00 g00_d1 g00_d2 g00_d3 g01 g01_d1 g01_d2 g01_d3 g10 g10_d1 g10_d2 g10_d3 g11 g11_d1 g11_d2 g11_d3 t0 dt theta y0_0_0 y0_0_1 w0_0_0 w0_0_1 w1_0_0 w1_0_1 dW0_0_0 dW0_0_1 from by simp only [Gen.adjloop_general_22_f0_d2_7d71de1c3128, Gen.adjloop_general_22_f0_d2_7c4c0451e7db, e1, e2, min_self]]
  rw [show Gen.adjloop_general_22_f1_d1_e3739d2f150a f0 f0_d1 f0_d2 f0_d3 f1 f1_d1 f1_d2 f1_d3 g00 g00_d1 g00_d2 g00_d3 g01 g01_d1 g01_d2 g01_d3 g10 g10_d1 g10_d2 g10_d3 g11 g11_d1 g11_d2 g11_d3 t0 dt theta y0_0_0 y0_0_1 w0_0_0 w0_0_1 w1_0_0 w1_0_1 dW0_0_0 dW0_0_1 = Gen.adjloop_general_22_f1_d1_d0ac0737681b f0 f0_d1 f0_d2 f0_d3 f1 f1_d1 f1_d2 f1_d3 g00 g00_d1 g00_d2 g00_d3 g01 g01_d1 g01_d2 g01_d3 g10 g10_d1 g10_d2 g10_d3 g11 g11_d1 g11_d2 g11_d3 t0 dt theta y0_0_0 y0_0_1 w0_0_0 w0_0_1 w1_0_0 w1_0_1 dW0_0_0 dW0_0_1 from by simp only [Gen.adjloop_general_22_f1_d1_e3739d2f150a, Gen.adjloop_general_22_f1_d1_d0ac0737681b, e1, e2, min_self]]
  rw [show Gen.adjloop_general_22_f1_d2_ff5e7643cd13 f0 f0_d1 f0_d2 f0_d3 f1 f1_d1 f1_d2 f1_d3 g00 g00_d1 g00_d2 g00_d3 g01 g01_d1 g01_d2 g01_d3 g10 g10_d1 g10_d2 g10_d3 g11 g11_d1 g11_d2 g11_d3 t0 dt theta y0_0_0 y0_0_1 w0_0_0 w0_0_1 w1_0_0 w1_0_1 dW0_0_0 dW0_0_1 = Gen.adjloop_general_22_f1_d2_43511aa619c2 f0 f0_d1 f0_d2 f0_d3 f1 f1_d1 f1_d2 f1_d3 g00 g00_d1 g00_d2 g00_d3 g01 g01_d1 g01_d2 g01_d3 g10 g10_d1 g10_d2 g10_d3 g11 g11_d1 g11_d2 g11_d3 t0 dt theta y0_0_0 y0_0_1 w0_0_0 w0_0_1 w1_0_0 w1_0_1 dW0_0_0 dW0_0_1 from by simp only [Gen.adjloop_general_22_f1_d2_ff5e7643cd13, Gen.adjloop_general_22_f1_d2_43511aa619c2, e1, e2, min_self]]
  rw [show Gen.adjloop_general_22_g00_d1_fb59be7d66fa f0 f0_d1 f0_d2 f0_d3 f1 f1_d1 f1_d2 f1_d3 g00 g00_d1 g00_d2 g00_d3 g01 g01_d1 g01_d2 g01_d3 g10 g10_d1 g10_d2 g10_d3 g11 g11_d1 g11_d2 g11_d3 t0 dt theta y0_0_0 y0_0_1 w0_0_0 w0_0_1 w1_0_0 w1_0_1 dW0_0_0 dW0_0_1 = Gen.adjloop_general_22_g00_d1_0e0ed7f41a61 f0 f0_d1 f0_d2 f0_d3 f1 f1_d1 f1_d2 f1_d3 g00 g00_d1 g00_d2 g00_d3 g01 g01_d1 g01_d2 g01_d3 g10 g10_d1 g10_d2 g10_d3 g11 g11_d1 g11_d2 g11_d3 t0 dt theta y0_0_0 y0_0_1 w0_0_0 w0_0_1 w1_0_0 w1_0_1 dW0_0_0 dW0_0_1 from by simp only [Gen.adjloop_general_22_g00_d1_fb59be7d66fa, Gen.adjloop_general_22_g00_d1_0e0ed7f41a61, e1, e2, min_self]]
  rw [show Gen.adjloop_general_22_g00_d2_e26ff264c485 f0 f0_d1 f0_d2 f0_d3 f1 f1_d1 f1_d2 f1_d3 g00 g00_d1 g00_d2 g00_d3 g01 g01_d1 g01_d2 g01_d3 g10 g10_d1 g10_d2 g10_d3 g11 g11_d1 g11_d2 g11_d3 t0 dt theta y0_0_0 y0_0_1 w0_0_0 w0_0_1 w1_0_0 w1_0_1 dW0_0_0 dW0_0_1 = Gen.adjloop_general_22_g00_d2_292668480761 f0 f0_d1 f0_d2 f0_d3 f1 f1_d1 f1_d2 f1_d3 g00 g00_d1 g00_d2 g00_d3 g01 g01_d1 g01_d2 g01_d3 g10 g10_d1 g10_d2 g10_d3 g11 g11_d1 g11_d2 g11_d3 t0 dt theta y0_0_0 y0_0_1 w0_0_0 w0_0_1 w1_0_0 w1_0_1 dW0_0_0 dW0_0_1 from by simp only [Gen.adjloop_general_22_g00_d2_e26ff264c485, Gen.adjloop_general_22_g00_d2_292668480761, e1, e2, min_self]]
  rw [show Gen.adjloop_general_22_g01_d1_91fbfbc93063 f0 f0_d1 f0_d2 f0_d3 f1 f1_d1 f1_d2 f1_d3 g00 g00_d1 g00_d2 g00_d3 g01 g01_d1 g01_d2 g01_d3 g10 g10_d1 g10_d2 g10_d3 g11 g11_d1 g11_d2 g11_d3 t0 dt theta y0_0_0 y0_0_1 w0_0_0 w0_0_1 w1_0_0 w1_0_1 dW0_0_0 dW0_0_1 = Gen.adjloop_general_22_g01_d1_004f124a13cb f0 f0_d1 f0_d2 f0_d3 f1 f1_d1 f1_d2 f1_d3 g00 g00_d1 g00_d2 g00_d3 g01 g01_d1 g01_d2 g01_d3 g10 g10_d1 g10_d2 g10_d3 g11 g11_d1 g11_d2 g11_d3 t0 dt theta y0_0_0 y0_0_1 w0_0_0 w0_0_1 w1_0_0 w1_0_1 dW0_0_0 dW0_0_1 from by simp only [Gen.adjloop_general_22_g01_d1_91fbfbc93063, Gen.adjloop_general_22_g01_d1_004f124a13cb, e1, e2, min_self]]
  rw [show Gen.adjloop_general_22_g01_d2_d4258cf3199e f0 f0_d1 f0_d2 f0_d3 f1 f1_d1 f1_d2 f1_d3 g00 g00_d1 g00_d2 g00_d3 g01 g01_d1 g01_d2 g01_d3 g10 g10_d1 g10_d2 g10_d3 g11 g11_d1 g11_d2 g11_d3 t0 dt theta y0_0_0 y0_0_1 w0_0_0 w0_0_1 w1_0_0 w1_0_1 dW0_0_0 dW0_0_1 = Gen.adjloop_general_22_g01_d2_6aaf1b3e33ff f0 f0_d1 f0_d2 f0_d3 f1 f1_d1 f1_d2 f1_d3 g00 g00_d1 g00_d2 g00_d3 g01 g01_d1 g01_d2 g01_d3 g10 g10_d1 g10_d2 g10_d3 g11 g11_d1 g11_d2 g11_d3 t0 dt theta y0_0_0 y0_0_1 w0_0_0 w0_0_1 w1_0_0 w1_0_1 dW0_0_0 dW0_0_1 from by simp only [Gen.adjloop_general_22_g01_d2_d4258cf3199e, Gen.adjloop_general_22_g01_d2_6aaf1b3e33ff, e1, e2, min_self]]
  rw [show Gen.adjloop_general_22_g10_d1_c8bb79da411e f0 f0_d1 f0_d2 f0_d3 f1 f1_d1 f1_d2 f1_d3 g00 g00_d1 g00_d2 g00_d3 g01 g01_d1 g01_d2 g01_d3 g10 g10_d1 g10_d2 g10_d3 g11 g11_d1 g11_d2 g11_d3 t0 dt theta y0_0_0 y0_0_1 w0_0_0 w0_0_1 w1_0_0 w1_0_1 dW0_0_0 dW0_0_1 = Gen.adjloop_general_22_g10_d1_1c1cb23786a4 f0 f0_d1 f0_d2 f0_d3 f1 f1_d1 f1_d2 f1_d3 g00 g00_d1 g00_d2 g00_d3 g01 g01_d1 g01_d2 g01_d3 g10 g10_d1 g10_d2 g10_d3 g11 g11_d1 g11_d2 g11_d3 t0 dt theta y0_0_0 y0_0_1 w0_0_0 w0_0_1 w1_0_0 w1_0_1 dW0_0_0 dW0_0_1 from by simp only [Gen.adjloop_general_22_g10_d1_c8bb79da411e, Gen.adjloop_general_22_g10_d1_1c1cb23786a4, e1, e2, min_self]]
  rw [show Gen.adjloop_general_22_g10_d2_34a16b053e26 f0 f0_d1 f0_d2 f0_d3 f1 f1_d1 f1_d2 f1_d3 g00 g00_d1 g00_d2 g00_d3 g01 g01_d1 g01_d2 g01_d3 g10 g10_d1 g10_d2 g10_d3 g11 g11_d1 g11_d2 g11_d3 t0 dt theta y0_0_0 y0_0_1 w0_0_0 w0_0_1 w1_0_0 w1_0_1 dW0_0_0 dW0_0_1 = Gen.adjloop_general_22_g10_d2_25a870ea714f f0 f0_d1 f0_d2 f0_d3 f1 f1_d1 f1_d2 f1_d3 g00 g00_d1 g00_d2 g00_d3 g01 g01_d1 g01_d2 g01_d3 g10 g10_d1 g10_d2 g10_d3 g11 g11_d1 g11_d2 g11_d3 t0 dt theta y0_0_0 y0_0_1 w0_0_0 w0_0_1 w1_0_0 w1_0_1 dW0_0_0 dW0_0_1 from by simp only [Gen.adjloop_general_22_g10_d2_34a16b053e26, Gen.adjloop_general_22_g10_d2_25a870ea714f, e1, e2, min_self]]
  rw [show Gen.adjloop_general_22_g11_d1_9c3c31565422 f0 f0_d1 f0_d2 f0_d3 f1 f1_d1 f1_d2 f1_d3 g00 g00_d1 g00_d2 g00_d3 g01 g01_d1 g01_d2 g01_d3 g10 g10_d1 g10_d2 g10_d3 g11 g11_d1 g11_d2 g11_d3 t0 dt theta y0_0_0 y0_0_1 w0_0_0 w0_0_1 w1_0_0 w1_0_1 dW0_0_0 dW0_0_1 = Gen.adjloop_general_22_g11_d1_9267b8cca483 f0 f0_d1 f0_d2 f0_d3 f1 f1_d1 f1_d2 f1_d3 g00 g00_d1 g00_d2 g00_d3 g01 g01_d1 g01_d2 g01_d3 g10 g10_d1 g10_d2 g10_d3 g11 g11_d1 g11_d2 g11_d3 t0 dt theta y0_0_0 y0_0_1 w0_0_0 w0_0_1 w1_0_0 w1_0_1 dW0_0_0 dW0_0_1 from by simp only [Gen.adjloop_general_22_g11_d1_9c3c31565422, Gen.adjloop_general_22_g11_d1_9267b8cca483, e1, e2, min_self]]
  rw [show Gen.adjloop_general_22_g11_d2_440c14275e3f f0 f0_d1 f0_d2 f0_d3 f1 f1_d1 f1_d2 f1_d3 g00 g00_d1 g00_d2 g00_d3 g01 g01_d1 g01_d2 g01_d3 g10 g10_d1 g10_d2 g10_d3 g11 g11_d1 g11_d2 g11_d3 t0 dt theta y0_0_0 y0_0_1 w0_0_0 w0_0_1 w1_0_0 w1_0_1 dW0_0_0 dW0_0_1 = Gen.adjloop_general_22_g11_d2_42fcf1b050b9 f0 f0_d1 f0_d2 f0_d3 f1 f1_d1 f1_d2 f1_d3 g00 g00_d1 g00_d2 g00_d3 g01 g01_d1 g01_d2 g01_d3 g10 g10_d1 g10_d2 g10_d3 g11 g11_d1 g11_d2 g11_d3 t0 dt theta y0_0_0 y0_0_1 w0_0_0 w0_0_1 w1_0_0 w1_0_1 dW0_0_0 dW0_0_1 from by simp only [Gen.adjloop_general_22_g11_d2_440c14275e3f, Gen.adjloop_general_22_g11_d2_42fcf1b050b9, e1, e2, min_self]]
  try generalize Gen.adjloop_general_22_f0_458d0b220324 f0 f0_d1 f0_d2 f0_d3 f1 f1_d1 f1_d2 f1_d3 g00 g00_d1 g00_d2 g00_d3 g01 g01_d1 g01_d2 g01_d3 g10 g10_d1 g10_d2 g10_d3 g11 g11_d1 g11_d2 g11_d3 t0 dt theta y0_0_0 y0_0_1 w0_0_0 w0_0_1 w1_0_0 w1_0_1 dW0_0_0 dW0_0_1 = a0
  try generalize Gen.adjloop_general_22_f0_8b7b27059830 f0 f0_d1 f0_d2 f0_d3 f1 f1_d1 f1_d2 f1_d3 g00 g00_d1 g00_d2 g00_d3 g01 g01_d1 g01_d2 g01_d3 g10 g10_d1 g10_d2 g10_d3 g11 g11_d1 g11_d2 g11_d3 t0 dt theta y0_0_0 y0_0_1 w0_0_0 w0_0_1 w1_0_0 w1_0_1 dW0_0_0 dW0_0_1 = a1
  try generalize Gen.adjloop_general_22_f0_d1_15634f09b6d9 f0 f0_d1 f0_d2 f0_d3 f1 f1_d1 f1_d2 f1_d3 g00 g00_d1 g00_d2 g00_d3 g01 g01_d1 g01_d2 g01_d3 g10 g10_d1 g10_d2 g10_d3 g11 g11_d1 g11_d2 g11_d3 t0 dt theta y0_0_0 y0_0_1 w0_0_0 w0_0_1 w1_0_0 w1_0_1 dW0_0_0 dW0_0_1 = a2
  try generalize Gen.adjloop_general_22_f0_d1_94e757153f17 f0 f0_d1 f0_d2 f0_d3 f1 f1_d1 f1_d2 f1_d3 g00 g00_d1 g00_d2 g00_d3 g01 g01_d1 g01_d2 g01_d3 g10 g10_d1 g10_d2 g10_d3 g11 g11_d1 g11_d2 g11_d3 t0 dt theta y0_0_0 y0_0_1 w0_0_0 w0_0_1 w1_0_0 w1_0_1 dW0_0_0 dW0_0_1 = a3
  try generalize Gen.adjloop_general_22_f0_d2_7c4c0451e7db f0 f0_d1 f0_d2 f0_d3 f1 f1_d1 f1_d2 f1_d3 g00 g00_d1 g00_d2 g00_d3 g01 g01_d1 g01_d2 g01_d3 g10 g10_d1 g10_d2 g10_d3 g11 g11_d1 g11_d2 g11_d3 t0 dt theta y0_0_0 y0_0_1 w0_0_0 w0_0_1 w1_0_0 w1_0_1 dW0_0_0 dW0_0_1 = a4
  try generalize Gen.adjloop_general_22_f0_d2_7d71de1c3128 f0 f0_d1 f0_d2 f0_d3 f1 f1_d1 f1_d2 f1_d3 g00 g00_d1 g00_d2 g00_d3 g01 g01_d1 g01_d2 g01_d3 g10 g10_d1 g10_d2 g10_d3 g11 g11_d1 g11_d2 g11_d3 t0 dt theta y0_0_0 y0_0_1 w0_0_0 w0_0_1 w1_0_0 w1_0_1 dW0_0_0 dW0_0_1 = a5
  try generalize Gen.adjloop_general_22_f0_d2_fb452e41c667 f0 f0_d1 f0_d2 f0_d3 f1 f1_d1 f1_d2 f1_d3 g00 g00_d1 g00_d2 g00_d3 g01 g01_d1 g01_d2 g01_d3 g10 g10_d1 g10_d2 g10_d3 g11 g11_d1 g11_d2 g11_d3 t0 dt theta y0_0_0 y0_0_1 w0_0_0 w0_0_1 w1_0_0 w1_0_1 dW0_0_0 dW0_0_1 = a6
  try generalize Gen.adjloop_general_22_f1_17941926937e f0 f0_d1 f0_d2 f0_d3 f1 f1_d1 f1_d2 f1_d3 g00 g00_d1 g00_d2 g00_d3 g01 g01_d1 g01_d2 g01_d3 g10 g10_d1 g10_d2 g10_d3 g11 g11_d1 g11_d2 g11_d3 t0 dt theta y0_0_0 y0_0_1 w0_0_0 w0_0_1 w1_0_0 w1_0_1 dW0_0_0 dW0_0_1 = a7
  try generalize Gen.adjloop_general_22_f1_7c0be7f7fbb3 f0 f0_d1 f0_d2 f0_d3 f1 f1_d1 f1_d2 f1_d3 g00 g00_d1 g00_d2 g00_d3 g01 g01_d1 g01_d2 g01_d3 g10 g10_d1 g10_d2 g10_d3 g11 g11_d1 g11_d2 g11_d3 t0 dt theta y0_0_0 y0_0_1 w0_0_0 w0_0_1 w1_0_0 w1_0_1 dW0_0_0 dW0_0_1 = a8
  try generalize Gen.adjloop_general_22_f1_d1_d0ac0737681b f0 f0_d1 f0_d2 f0_d3 f1 f1_d1 f1_d2 f1_d3 g00 g00_d1 g00_d2 g00_d3 g01 g01_d1 g01_d2 g01_d3 g10 g10_d1 g10_d2 g10_d3 g11 g11_d1 g11_d2 g11_d3 t0 dt theta y0_0_0 y0_0_1 w0_0_0 w0_0_1 w1_0_0 w1_0_1 dW0_0_0 dW0_0_1 = a9
  try generalize Gen.adjloop_general_22_f1_d1_e3739d2f150a f0 f0_d1 f0_d2 f0_d3 f1 f1_d1 f1_d2 f1_d3 g00 g00_d1 g00_d2 g00_d3 g01 g01_d1 g01_d2 g01_d3 g10 g10_d1 g10_d2 g10_d3 g11 g11_d1 g11_d2 g11_d3 t0 dt theta y0_0_0 y0_0_1 w0_0_0 w0_0_1 w1_0_0 w1_0_1 dW0_0_0 dW0_0_1 = a10
  try generalize Gen.adjloop_general_22_f1_d2_43511aa619c2 f0 f0_d1 f0_d2 f0_d3 f1 f1_d1 f1_d2 f1_d3 g00 g00_d1 g00_d2 g00_d3 g01 g01_d1 g01_d2 g01_d3 g10 g10_d1 g10_d2 g10_d3 g11 g11_d1 g11_d2 g11_d3 t0 dt theta y0_0_0 y0_0_1 w0_0_0 w0_0_1 w1_0_0 w1_0_1 dW0_0_0 dW0_0_1 = a11
  try generalize Gen.adjloop_general_22_f1_d2_8d6b833a79b6 f0 f0_d1 f0_d2 f0_d3 f1 f1_d1 f1_d2 f1_d3 g00 g00_d1 g00_d2 g00_d3 g01 g01_d1 g01_d2 g01_d3 g10 g10_d1 g10_d2 g10_d3 g11 g11_d1 g11_d2 g11_d3 t0 dt theta y0_0_0 y0_0_1 w0_0_0 w0_0_1 w1_0_0 w1_0_1 dW0_0_0 dW0_0_1 = a12
  try generalize Gen.adjloop_general_22_f1_d2_ff5e7643cd13 f0 f0_d1 f0_d2 f0_d3 f1 f1_d1 f1_d2 f1_d3 g00 g00_d1 g00_d2 g00_d3 g01 g01_d1 g01_d2 g01_d3 g10 g10_d1 g10_d2 g10_d3 g11 g11_d1 g11_d2 g11_d3 t0 dt theta y0_0_0 y0_0_1 w0_0_0 w0_0_1 w1_0_0 w1_0_1 dW0_0_0 dW0_0_1 = a13
  try generalize Gen.adjloop_general_22_g00_462e2db3a013 f0 f0_d1 f0_d2 f0_d3 f1 f1_d1 f1_d2 f1_d3 g00 g00_d1 g00_d2 g00_d3 g01 g01_d1 g01_d2 g01_d3 g10 g10_d1 g10_d2 g10_d3 g11 g11_d1 g11_d2 g11_d3 t0 dt theta y0_0_0 y0_0_1 w0_0_0 w0_0_1 w1_0_0 w1_0_1 dW0_0_0 dW0_0_1 = a14
  try generalize Gen.adjloop_general_22_g00_9e18be45a5ce f0 f0_d1 f0_d2 f0_d3 f1 f1_d1 f1_d2 f1_d3 g00 g00_d1 g00_d2 g00_d3 g01 g01_d1 g01_d2 g01_d3 g10 g10_d1 g10_d2 g10_d3 g11 g11_d1 g11_d2 g11_d3 t0 dt theta y0_0_0 y0_0_1 w0_0_0 w0_0_1 w1_0_0 w1_0_1 dW0_0_0 dW0_0_1 = a15
  try generalize Gen.adjloop_general_22_g00_d1_0e0ed7f41a61 f0 f0_d1 f0_d2 f0_d3 f1 f1_d1 f1_d2 f1_d3 g00 g00_d1 g00_d2 g00_d3 g01 g01_d1 g01_d2 g01_d3 g10 g10_d1 g10_d2 g10_d3 g11 g11_d1 g11_d2 g11_d3 t0 dt theta y0_0_0 y0_0_1 w0_0_0 w0_0_1 w1_0_0 w1_0_1 dW0_0_0 dW0_0_1 = a16
  try generalize Gen.adjloop_general_22_g00_d1_fb59be7d66fa f0 f0_d1 f0_d2 f0_d3 f1 f1_d1 f1_d2 f1_d3 g00 g00_d1 g00_d2 g00_d3 g01 g01_d1 g01_d2 g01_d3 g10 g10_d1 g10_d2 g10_d3 g11 g11_d1 g11_d2 g11_d3 t0 dt theta y0_0_0 y0_0_1 w0_0_0 w0_0_1 w1_0_0 w1_0_1 dW0_0_0 dW0_0_1 = a17
  try generalize Gen.adjloop_general_22_g00_d2_292668480761 f0 f0_d1 f0_d2 f0_d3 f1 f1_d1 f1_d2 f1_d3 g00 g00_d1 g00_d2 g00_d3 g01 g01_d1 g01_d2 g01_d3 g10 g10_d1 g10_d2 g10_d3 g11 g11_d1 g11_d2 g11_d3 t0 dt theta y0_0_0 y0_0_1 w0_0_0 w0_0_1 w1_0_0 w1_0_1 dW0_0_0 dW0_0_1 = a18
  try generalize Gen.adjloop_general_22_g00_d2_957737feac38 f0 f0_d1 f0_d2 f0_d3 f1 f1_d1 f1_d2 f1_d3 g00 g00_d1 g00_d2 g00_d3 g01 g01_d1 g01_d2 g01_d3 g10 g10_d1 g10_d2 g10_d3 g11 g11_d1 g11_d2 g11_d3 t0 dt theta y0_0_0 y0_0_1 w0_0_0 w0_0_1 w1_0_0 w1_0_1 dW0_0_0 dW0_0_1 = a19
  try generalize Gen.adjloop_general_22_g00_d2_e26ff264c485 f0 f0_d1 f0_d2 f0_d3 f1 f1_d1 f1_d2 f1_d3 g00 g00_d1 g00_d2 g00_d3 g01 g01_d1 g01_d2 g01_d3 g10 g10_d1 g10_d2 g10_d3 g11 g11_d1 g11_d2 g11_d3 t0 dt theta y0_0_0 y0_0_1 w0_0_0 w0_0_1 w1_0_0 w1_0_1 dW0_0_0 dW0_0_1 = a20
  try generalize Gen.adjloop_general_22_g01_8f73612fb0d7 f0 f0_d1 f0_d2 f0_d3 f1 f1_d1 f1_d2 f1_d3 g00 g00_d1 g00_d2 g00_d3 g01 g01_d1 g01_d2 g01_d3 g10 g10_d1 g10_d2 g10_d3 g11 g11_d1 g11_d2 g11_d3 t0 dt theta y0_0_0 y0_0_1 w0_0_0 w0_0_1 w1_0_0 w1_0_1 dW0_0_0 dW0_0_1 = a21
  try generalize Gen.adjloop_general_22_g01_b8238ff245ae f0 f0_d1 f0_d2 f0_d3 f1 f1_d1 f1_d2 f1_d3 g00 g00_d1 g00_d2 g00_d3 g01 g01_d1 g01_d2 g01_d3 g10 g10_d1 g10_d2 g10_d3 g11 g11_d1 g11_d2 g11_d3 t0 dt theta y0_0_0 y0_0_1 w0_0_0 w0_0_1 w1_0_0 w1_0_1 dW0_0_0 dW0_0_1 = a22
  try generalize Gen.adjloop_general_22_g01_d1_004f124a13cb f0 f0_d1 f0_d2 f0_d3 f1 f1_d1 f1_d2 f1_d3 g00 g00_d1 g00_d2 g00_d3 g01 g01_d1 g01_d2 g01_d3 g10 g10_d1 g10_d2 g10_d3 g11 g11_d1 g11_d2 g11_d3 t0 dt theta y0_0_0 y0_0_1 w0_0_0 w0_0_1 w1_0_0 w1_0_1 dW0_0_0 dW0_0_1 = a23
  try generalize Gen.adjloop_general_22_g01_d1_91fbfbc93063 f0 f0_d1 f0_d2 f0_d3 f1 f1_d1 f1_d2 f1_d3 g00 g00_d1 g00_d2 g00_d3 g01 g01_d1 g01_d2 g01_d3 g10 g10_d1 g10_d2 g10_d3 g11 g11_d1 g11_d2 g11_d3 t0 dt theta y0_0_0 y0_0_1 w0_0_0 w0_0_1 w1_0_0 w1_0_1 dW0_0_0 dW0_0_1 = a24
  try generalize Gen.adjloop_general_22_g01_d2_57641ef8b8ab f0 f0_d1 f0_d2 f0_d3 f1 f1_d1 f1_d2 f1_d3 g00 g00_d1 g00_d2 g00_d3 g01 g01_d1 g01_d2 g01_d3 g10 g10_d1 g10_d2 g10_d3 g11 g11_d1 g11_d2 g11_d3 t0 dt theta y0_0_0 y0_0_1 w0_0_0 w0_0_1 w1_0_0 w1_0_1 dW0_0_0 dW0_0_1 = a25
  try generalize Gen.adjloop_general_22_g01_d2_6aaf1b3e33ff f0 f0_d1 f0_d2 f0_d3 f1 f1_d1 f1_d2 f1_d3 g00 g00_d1 g00_d2 g00_d3 g01 g01_d1 g01_d2 g01_d3 g10 g10_d1 g10_d2 g10_d3 g11 g11_d1 g11_d2 g11_d3 t0 dt theta y0_0_0 y0_0_1 w0_0_0 w0_0_1 w1_0_0 w1_0_1 dW0_0_0 dW0_0_1 = a26
  try generalize Gen.adjloop_general_22_g01_d2_d4258cf3199e f0 f0_d1 f0_d2 f0_d3 f1 f1_d1 f1_d2 f1_d3 g00 g00_d1 g00_d2 g00_d3 g01 g01_d1 g01_d2 g01_d3 g10 g10_d1 g10_d2 g10_d3 g11 g11_d1 g11_d2 g11_d3 t0 dt theta y0_0_0 y0_0_1 w0_0_0 w0_0_1 w1_0_0 w1_0_1 dW0_0_0 dW0_0_1 = a27
  try generalize Gen.adjloop_general_22_g10_cc8ea48e41b6 f0 f0_d1 f0_d2 f0_d3 f1 f1_d1 f1_d2 f1_d3 g00 g00_d1 g00_d2 g00_d3 g01 g01_d1 g01_d2 g01_d3 g10 g10_d1 g10_d2 g10_d3 g11 g11_d1 g11_d2 g11_d3 t0 dt theta y0_0_0 y0_0_1 w0_0_0 w0_0_1 w1_0_0 w1_0_1 dW0_0_0 dW0_0_1 = a28
  try generalize Gen.adjloop_general_22_g10_d1_1c1cb23786a4 f0 f0_d1 f0_d2 f0_d3 f1 f1_d1 f1_d2 f1_d3 g00 g00_d1 g00_d2 g00_d3 g01 g01_d1 g01_d2 g01_d3 g10 g10_d1 g10_d2 g10_d3 g11 g11_d1 g11_d2 g11_d3 t0 dt theta y0_0_0 y0_0_1 w0_0_0 w0_0_1 w1_0_0 w1_0_1 dW0_0_0 dW0_0_1 = a29
  try generalize Gen.adjloop_general_22_g10_d1_c8bb79da411e f0 f0_d1 f0_d2 f0_d3 f1 f1_d1 f1_d2 f1_d3 g00 g00_d1 g00_d2 g00_d3 g01 g01_d1 g01_d2 g01_d3 g10 g10_d1 g10_d2 g10_d3 g11 g11_d1 g11_d2 g11_d3 t0 dt theta y0_0_0 y0_0_1 w0_0_0 w0_0_1 w1_0_0 w1_0_1 dW0_0_0 dW0_0_1 = a30
  try generalize Gen.adjloop_general_22_g10_d2_25a870ea714f f0 f0_d1 f0_d2 f0_d3 f1 f1_d1 f1_d2 f1_d3 g00 g00_d1 g00_d2 g00_d3 g01 g01_d1 g01_d2 g01_d3 g10 g10_d1 g10_d2 g10_d3 g11 g11_d1 g11_d2 g11_d3 t0 dt theta y0_0_0 y0_0_1 w0_0_0 w0_0_1 w1_0_0 w1_0_1 dW0_0_0 dW0_0_1 = a31
  try generalize Gen.adjloop_general_22_g10_d2_34a16b053e26 f0 f0_d1 f0_d2 f0_d3 f1 f1_d1 f1_d2 f1_d3 g00 g00_d1 g00_d2 g00_d3 g01 g01_d1 g01_d2 g01_d3 g10 g10_d1 g10_d2 g10_d3 g11 g11_d1 g11_d2 g11_d3 t0 dt theta y0_0_0 y0_0_1 w0_0_0 w0_0_1 w1_0_0 w1_0_1 dW0_0_0 dW0_0_1 = a32
  try generalize Gen.adjloop_general_22_g10_d2_da150e4179e3 f0 f0_d1 f0_d2 f0_d3 f1 f1_d1 f1_d2 f1_d3 g00 g00_d1 g00_d2 g00_d3 g01 g01_d1 g01_d2 g01_d3 g10 g10_d1 g10_d2 g10_d3 g11 g11_d1 g11_d2 g11_d3 t0 dt theta y0_0_0 y0_0_1 w0_0_0 w0_0_1 w1_0_0 w1_0_1 dW0_0_0 dW0_0_1 = a33
  try generalize Gen.adjloop_general_22_g10_dd89bcb9088f f0 f0_d1 f0_d2 f0_d3 f1 f1_d1 f1_d2 f1_d3 g00 g00_d1 g00_d2 g00_d3 g01 g01_d1 g01_d2 g01_d3 g10 g10_d1 g10_d2 g10_d3 g11 g11_d1 g11_d2 g11_d3 t0 dt theta y0_0_0 y0_0_1 w0_0_0 w0_0_1 w1_0_0 w1_0_1 dW0_0_0 dW0_0_1 = a34
  try generalize Gen.adjloop_general_22_g11_0908a869832b f0 f0_d1 f0_d2 f0_d3 f1 f1_d1 f1_d2 f1_d3 g00 g00_d1 g00_d2 g00_d3 g01 g01_d1 g01_d2 g01_d3 g10 g10_d1 g10_d2 g10_d3 g11 g11_d1 g11_d2 g11_d3 t0 dt theta y0_0_0 y0_0_1 w0_0_0 w0_0_1 w1_0_0 w1_0_1 dW0_0_0 dW0_0_1 = a35
  try generalize Gen.adjloop_general_22_g11_7674affb00fc f0 f0_d1 f0_d2 f0_d3 f1 f1_d1 f1_d2 f1_d3 g00 g00_d1 g00_d2 g00_d3 g01 g01_d1 g01_d2 g01_d3 g10 g10_d1 g10_d2 g10_d3 g11 g11_d1 g11_d2 g11_d3 t0 dt theta y0_0_0 y0_0_1 w0_0_0 w0_0_1 w1_0_0 w1_0_1 dW0_0_0 dW0_0_1 = a36
  try generalize Gen.adjloop_general_22_g11_d1_9267b8cca483 f0 f0_d1 f0_d2 f0_d3 f1 f1_d1 f1_d2 f1_d3 g00 g00_d1 g00_d2 g00_d3 g01 g01_d1 g01_d2 g01_d3 g10 g10_d1 g10_d2 g10_d3 g11 g11_d1 g11_d2 g11_d3 t0 dt theta y0_0_0 y0_0_1 w0_0_0 w0_0_1 w1_0_0 w1_0_1 dW0_0_0 dW0_0_1 = a37
  try generalize Gen.adjloop_general_22_g11_d1_9c3c31565422 f0 f0_d1 f0_d2 f0_d3 f1 f1_d1 f1_d2 f1_d3 g00 g00_d1 g00_d2 g00_d3 g01 g01_d1 g01_d2 g01_d3 g10 g10_d1 g10_d2 g10_d3 g11 g11_d1 g11_d2 g11_d3 t0 dt theta y0_0_0 y0_0_1 w0_0_0 w0_0_1 w1_0_0 w1_0_1 dW0_0_0 dW0_0_1 = a38
  try generalize Gen.adjloop_general_22_g11_d2_42fcf1b050b9 f0 f0_d1 f0_d2 f0_d3 f1 f1_d1 f1_d2 f1_d3 g00 g00_d1 g00_d2 g00_d3 g01 g01_d1 g01_d2 g01_d3 g10 g10_d1 g10_d2 g10_d3 g11 g11_d1 g11_d2 g11_d3 t0 dt theta y0_0_0 y0_0_1 w0_0_0 w0_0_1 w1_0_0 w1_0_1 dW0_0_0 dW0_0_1 = a39
  try generalize Gen.adjloop_general_22_g11_d2_440c14275e3f f0 f0_d1 f0_d2 f0_d3 f1 f1_d1 f1_d2 f1_d3 g00 g00_d1 g00_d2 g00_d3 g01 g01_d1 g01_d2 g01_d3 g10 g10_d1 g10_d2 g10_d3 g11 g11_d1 g11_d2 g11_d3 t0 dt theta y0_0_0 y0_0_1 w0_0_0 w0_0_1 w1_0_0 w1_0_1 dW0_0_0 dW0_0_1 = a40
  try generalize Gen.adjloop_general_22_g11_d2_be6014df2f6c f0 f0_d1 f0_d2 f0_d3 f1 f1_d1 f1_d2 f1_d3 g00 g00_d1 g00_d2 g00_d3 g01 g01_d1 g01_d2 g01_d3 g10 g10_d1 g10_d2 g10_d3 g11 g11_d1 g11_d2 g11_d3 t0 dt theta y0_0_0 y0_0_1 w0_0_0 w0_0_1 w1_0_0 w1_0_1 dW0_0_0 dW0_0_1 = a41
  try (first | ring | (field_simp; ring))

set_option maxHeartbeats 4000000 in
/-- `adjloop_general_22`: `ad_th` = `bp_th` -/
theorem adjloop_general_22_ad_th (f0 : K → K → K → K → K) (f0_d1 : K → K → K → K → K) (f0_d2 : K → K → K → K → K) (f0_d3 : K → K → K → K → K) (f1 : K → K → K → K → K) (f1_d1 : K → K → K → K → K) (f1_d2 : K → K → K → K → K) (f1_d3 : K → K → K → K → K) (g00 : K → K → K → K → K) (g00_d1 : K → K → K → K → K) (g00_d2 : K → K → K → K → K) (g00_d3 : K → K → K → K → K) (g01 : K → K → K → K → K) (g01_d1 : K → K → K → K → K) (g01_d2 : K → K → K → K → K) (g01_d3 : K → K → K → K → K) (g10 : K → K → K → K → K) (g10_d1 : K → K → K → K → K) (g10_d2 : K → K → K → K → K) (g10_d3 : K → K → K → K → K) (g11 : K → K → K → K → K) (g11_d1 : K → K → K → K → K) (g11_d2 : K → K → K → K → K) (g11_d3 : K → K → K → K → K) (t0 dt theta y0_0_0 y0_0_1 w0_0_0 w0_0_1 w1_0_0 w1_0_1 dW0_0_0 dW0_0_1 : K) (hdt : dt ≠ 0) :
    Gen.adjloop_general_22_ad_th f0 f0_d1 f0_d2 f0_d3 f1 f1_d1 f1_d2 f1_d3 g00 g00_d1 g00_d2 g00_d3 g01 g01_d1 g01_d2 g01_d3 g10 g10_d1 g10_d2 g10_d3 g11 g11_d1 g11_d2 g11_d3 t0 dt theta y0_0_0 y0_0_1 w0_0_0 w0_0_1 w1_0_0 w1_0_1 dW0_0_0 dW0_0_1 = Gen.adjloop_general_22_bp_th f0 f0_d1 f0_d2 f0_d3 f1 f1_d1 f1_d2 f1_d3 g00 g00_d1 g00_d2 g00_d3 g01 g01_d1 g01_d2 g01_d3 g10 g10_d1 g10_d2 g10_d3 g11 g11_d1 g11_d2 g11_d3 t0 dt theta y0_0_0 y0_0_1 w0_0_0 w0_0_1 w1_0_0 w1_0_1 dW0_0_0 dW0_0_1 := by
  have e1 : t0 + 0 * dt + dt = t0 + 1 * dt := by ring
  have e2 : -(t0 + 1 * dt) + dt = -(t0 + 0 * dt) := by ring
  have e3 : -(t0 + 0 * dt) - -(t0 + 1 * dt) = dt := by ring
  have e4 : t0 + 1 * dt - (t0 + 0 * dt) = dt := by ring
  simp only [Gen.adjloop_general_22_ad_th, Gen.adjloop_general_22_bp_th, neg_neg, e1, e2, min_self, e3, e4]
  rw [show Gen.adjloop_general_22_f0_d1_94e757153f17 f0 f0_d1 f0_d2 f0_d3 f1 f1_d1 f1_d2 f1_d3 g00 g00_d1 g00_d2 g00_d3 g01 g01_d1 g01_d2 g01_d3 g10 g10_d1 g10_d2 g10_d3 g11 g11_d1 g11_d2 g11_d3 t0 dt theta y0_0_0 y0_0_1 w0_0_0 w0_0_1 w1_0_0 w1_0_1 dW0_0_0 dW0_0_1 = Gen.adjloop_general_22_f0_d1_15634f09b6d9 f0 f0_d1 f0_d2 f0_d3 f1 f1_d1 f1_d2 f1_d3 g00 g00_d1 g00_d2 g00_d3 g01 g01_d1 g01_d2 g01_d3 g10 g10_d1 g10_d2 g10_d3 g11 g11_d1 g11_d2 g11_d3 t0 dt theta y0_0_0 y0_0_1 w0_0_0 w0_0_1 w1_0_0 w1_0_1 dW0_0_0 dW0_0_1 from by simp only [Gen.adjloop_general_22_f0_d1_94e757153f17, Gen.adjloop_general_22_f0_d1_15634f09b6d9, e1, e2, min_self]]
  rw [show Gen.adjloop_general_22_f0_d2_7d71de1c3128 f0 f0_d1 f0_d2 f0_d3 f1 f1_d1 f1_d2 f1_d3 g00 g00_d1 g00_d2 g00_d3 g01 g01_d1 g01_d2 g01_d3 g10 g10_d1 g10_d2 g10_d3 g11 g11_d1 g11_d2 g11_d3 t0 dt theta y0_0_0 y0_0_1 w0_0_0 w0_0_1 w1_0_0 w1_0_1 dW0_0_0 dW0_0_1 = Gen.adjloop_general_22_f0_d2_7c4c0451e7db f0 f0_d1 f0_d2 f0_d3 f1 f1_d1 f1_d2 f1_d3 g00 g00_d1 g00_d2 g00_d3 g01 g01_d1 g01_d2 g01_d3 g10 g10_d1 g10_d2 g10_d3 g11 g11_d1 g11_d2 g11_d3 t0 dt theta y0_0_0 y0_0_1 w0_0_0 w0_0_1 w1_0_0 w1_0_1 dW0_0_0 dW0_0_1 from by simp only [Gen.adjloop_general_22_f0_d2_7d71de1c3128, Gen.adjloop_general_22_f0_d2_7c4c0451e7db, e1, e2, min_self]]
  rw [show Gen.adjloop_general_22_f0_d3_81cec8de932b f0 f0_d1 f0_d2 f0_d3 f1 f1_d1 f1_d2 f1_d3 g00 g00_d1 g00_d2 g00_d3 g01 g01_d1 g01_d2 g01_d3 g10 g10_d1 g10_d2 g10_d3 g11 g11_d1 g11_d2 g11_d3 t0 dt theta y0_0_0 y0_0_1 w0_0_0 w0_0_1 w1_0_0 w1_0_1 dW0_0_0 dW0_0_1 = Gen.adjloop_general_22_f0_d3_05486feaf4e9 f0 f0_d1 f0_d2 f0_d3 f1 f1_d1 f1_d2 f1_d3 g00 g00_d1 g00_d2 g00_d3 g01 g01_d1 g01_d2 g01_d3 g10 g10_d1 g10_d2 g10_d3 g11 g11_d1 g11_d2 g11_d3 t0 dt theta y0_0_0 y0_0_1 w0_0_0 w0_0_1 w1_0_0 w1_0_1 dW0_0_0 dW0_0_1 from by simp only [Gen.adjloop_general_22_f0_d3_81cec8de932b, Gen.adjloop_general_22_f0_d3_05486feaf4e9, e1, e2, min_self]]
  rw [show Gen.adjloop_general_22_f1_d1_e3739d2f150a f0 f0_d1 f0_d2 f0_d3 f1 f1_d1 f1_d2 f1_d3 g00 g00_d1 g00_d2 g00_d3 g01 g01_d1 g01_d2 g01_d3 g10 g10_d1 g10_d2 g10_d3 g11 g11_d1 g11_d2 g11_d3 t0 dt theta y0_0_0 y0_0_1 w0_0_0 w0_0_1 w1_0_0 w1_0_1 dW0_0_0 dW0_0_1 = Gen.adjloop_general_22_f1_d1_d0ac0737681b f0 f0_d1 f0_d2 f0_d3 f1 f1_d1 f1_d2 f1_d3 g00 g00_d1 g00_d2 g00_d3 g01 g01_d1 g01_d2 g01_d3 g10 g10_d1 g10_d2 g10_d3 g11 g11_d1 g11_d2 g11_d3 t0 dt theta y0_0_0 y0_0_1 w0_0_0 w0_0_1 w1_0_0 w1_0_1 dW0_0_0 dW0_0_1 from by simp only [Gen.adjloop_general_22_f1_d1_e3739d2f150a, Gen.adjloop_general_22_f1_d1_d0ac0737681b, e1, e2, min_self]]
  rw [show Gen.adjloop_general_22_f1_d2_ff5e7643cd13 f0 f0_d1 f0_d2 f0_d3 f1 f1_d1 f1_d2 f1_d3 g00 g00_d1 g00_d2 g00_d3 g01 g01_d1 g01_d2 g01_d3 g10 g10_d1 g10_d2 g10_d3 g11 g11_d1 g11_d2 g11_d3 t0 dt theta y0_0_0 y0_0_1 w0_0_0 w0_0_1 w1_0_0 w1_0_1 dW0_0_0 dW0_0_1 = Gen.adjloop_general_22_f1_d2_43511aa619c2 f0 f0_d1 f0_d2 f0_d3 f1 f1_d1 f1_d2 f1_d3 g00 g00_d1 g00_d2 g00_d3 g01 g01_d1 g01_d2 g01_d3 g10 g10_d1 g10_d2 g10_d3 g11 g11_d1 g11_d2 g11_d3 t0 dt theta y0_0_0 y0_0_1 w0_0_0 w0_0_1 w1_0_0 w1_0_1 dW0_0_0 dW0_0_1 from by simp only [Gen.adjloop_general_22_f1_d2_ff5e7643cd13, Gen.adjloop_general_22_f1_d2_43511aa619c2, e1, e2, min_self]]
  rw [show Gen.adjloop_general_22_f1_d3_af71255d8127 f0 f0_d1 f0_d2 f0_d3 f1 f1_d1 f1_d2 f1_d3 g00 g00_d1 g00_d2 g00_d3 g01 g01_d1 g01_d2 g01_d3 g10 g10_d1 g10_d2 g10_d3 g11 g11_d1 g11_d2 g11_d3 t0 dt theta y0_0_0 y0_0_1 w0_0_0 w0_0_1 w1_0_0 w1_0_1 dW0_0_0 dW0_0_1 = Gen.adjloop_general_22_f1_d3_19ddc0b1cd8d f0 f0_d1 f0_d2 f0_d3 f1 f1_d1 f1_d2 f1_d3 g00 g00_d1 g00_d2 g00_d3 g01 g01_d1 g01_d2 g01_d3 g10 g10_d1 g10_d2 g10_d3 g11 g11_d1 g11_d2 g11_d3 t0 dt theta y0_0_0 y0_0_1 w0_0_0 w0_0_1 w1_0_0 w1_0_1 dW0_0_0 dW0_0_1 from by simp only [Gen.adjloop_general_22_f1_d3_af71255d8127, Gen.adjloop_general_22_f1_d3_19ddc0b1cd8d, e1, e2, min_self]]
  rw [show Gen.adjloop_general_22_g00_d1_fb59be7d66fa f0 f0_d1 f0_d2 f0_d3 f1 f1_d1 f1_d2 f1_d3 g00 g00_d1 g00_d2 g00_d3 g01 g01_d1 g01_d2 g01_d3 g10 g10_d1 g10_d2 g10_d3 g11 g11_d1 g11_d2 g11_d3 t0 dt theta y0_0_0 y0_0_1 w0_0_0 w0_0_1 w1_0_0 w1_0_1 dW0_0_0 dW0_0_1 = Gen.adjloop_general_22_g00_d1_0e0ed7f41a61 f0 f0_d1 f0_d2 f0_d3 f1 f1_d1 f1_d2 f1_d3 g00 g00_d1 g00_d2 g00_d3 g01 g01_d1 g01_d2 g01_d3 g10 g10_d1 g10_d2 g10_d3 g11 g11_d1 g11_d2 g11_d3 t0 dt theta y0_0_0 y0_0_1 w0_0_0 w0_0_1 w1_0_0 w1_0_1 dW0_0_0 dW0_0_1 from by simp only [Gen.adjloop_general_22_g00_d1_fb59be7d66fa, Gen.adjloop_general_22_g00_d1_0e0ed7f41a61, e1, e2, min_self]]
  rw [show Gen.adjloop_general_22_g00_d2_e26ff264c485 f0 f0_d1 f0_d2 f0_d3 f1 f1_d1 f1_d2 f1_d3 g00 g00_d1 g00_d2 g00_d3 g01 g01_d1 g01_d2 g01_d3 g10 g10_d1 g10_d2 g10_d3 g11 g11_d1 g11_d2 g11_d3 t0 dt theta y0_0_0 y0_0_1 w0_0_0 w0_0_1 w1_0_0 w1_0_1 dW0_0_0 dW0_0_1 = Gen.adjloop_general_22_g00_d2_292668480761 f0 f0_d1 f0_d2 f0_d3 f1 f1_d1 f1_d2 f1_d3 g00 g00_d1 g00_d2 g00_d3 g01 g01_d1 g01_d2 g01_d3 g10 g10_d1 g10_d2 g10_d3 g11 g11_d1 g11_d2 g11_d3 t0 dt theta y0_0_0 y0_0_1 w0_0_0 w0_0_1 w1_0_0 w1_0_1 dW0_0_0 dW0_0_1 from by simp only [Gen.adjloop_general_22_g00_d2_e26ff264c485, Gen.adjloop_general_22_g00_d2_292668480761, e1, e2, min_self]]
  rw [show Gen.adjloop_general_22_g00_d3_ea35ffaa17b4 f0 f0_d1 f0_d2 f0_d3 f1 f1_d1 f1_d2 f1_d3 g00 g00_d1 g00_d2 g00_d3 g01 g01_d1 g01_d2 g01_d3 g10 g10_d1 g10_d2 g10_d3 g11 g11_d1 g11_d2 g11_d3 t0 dt theta y0_0_0 y0_0_1 w0_0_0 w0_0_1 w1_0_0 w1_0_1 dW0_0_0 dW0_0_1 = Gen.adjloop_general_22_g00_d3_bdcaed58cf32 f0 f0_d1 f0_d2 f0_d3 f1 f1_d1 f1_d2 f1_d3 g00 g00_d1 g00_d2 g00_d3 g01 g01_d1 g01_d2 g01_d3 g10 g10_d1 g10_d2 g10_d3 g11 g11_d1 g11_d2 g11_d3 t0 dt theta y0_0_0 y0_0_1 w0_0_0 w0_0_1 w1_0_0 w1_0_1 dW0_0_0 dW0_0_1 from by simp only [Gen.adjloop_general_22_g00_d3_ea35ffaa17b4, Gen.adjloop_general_22_g00_d3_bdcaed58cf32, e1, e2, min_self]]
  rw [show Gen.adjloop_general_22_g01_d1_91fbfbc93063 f0 f0_d1 f0_d2 f0_d3 f1 f1_d1 f1_d2 f1_d3 g00 g00_d1 g00_d2 g00_d3 g01 g01_d1 g01_d2 g01_d3 g10 g10_d1 g10_d2 g10_d3 g11 g11_d1 g11_d2 g11_d3 t0 dt theta y0_0_0 y0_0_1 w0_0_0 w0_0_1 w1_0_0 w1_0_1 dW0_0_0 dW0_0_1 = Gen.adjloop_general_22_g01_d1_004f124a13cb f0 f0_d1 f0_d2 f0_d3 f1 f1_d1 f1_d2 f1_d3 g00 g00_d1 g00_d2 g00_d3 g01 g01_d1 g01_d2 g01_d3 g10 g10_d1 g10_d2 g10_d3 g11 g11_d1 g11_d2 g11_d3 t0 dt theta y0_0_0 y0_0_1 w0_0_0 w0_0_1 w1_0_0 w1_0_1 dW0_0_0 dW0_0_1 from by simp only [Gen.adjloop_general_22_g01_d1_91fbfbc93063, Gen.adjloop_general_22_g01_d1_004f124a13cb, e1, e2, min_self]]
  rw [show Gen.adjloop_general_22_g01_d2_d4258cf3199e f0 f0_d1 f0_d2 f0_d3 f1 f1_d1 f1_d2 f1_d3 g00 g00_d1 g00_d2 g00_d3 g01 g01_d1 g01_d2 g01_d3 g10 g10_d1 g10_d2 g10_d3 g11 g11_d1 g11_d2 g11_d3 t0 dt theta y0_0_0 y0_0_1 w0_0_0 w0_0_1 w1_0_0 w1_0_1 dW0_0_0 dW0_0_1 = Gen.adjloop_general_22_g01_d2_6aaf1b3e33ff f0 f0_d1 f0_d2 f0_d3 f1 f1_d1 f1_d2 f1_d3 g00 g00_d1 g00_d2 g00_d3 g01 g01_d1 g01_d2 g01_d3 g10 g10_d1 g10_d2 g10_d3 g11 g11_d1 g11_d2 g11_d3 t0 dt theta y0_0_0 y0_0_1 w0_0_0 w0_0_1 w1_0_0 w1_0_1 dW0_0_0 dW0_0_1 from by simp only [Gen.adjloop_general_22_g01_d2_d4258cf3199e, Gen.adjloop_general_22_g01_d2_6aaf1b3e33ff, e1, e2, min_self]]
  rw [show Gen.adjloop_general_22_g01_d3_b4420990794d f0 f0_d1 f0_d2 f0_d3 f1 f1_d1 f1_d2 f1_d3 g00 g00_d1 g00_d2 g00_d3 g01 g01_d1 g01_d2 g01_d3 g10 g10_d1 g10_d2 g10_d3 g11 g11_d1 g11_d2 g11_d3 t0 dt theta y0_0_0 y0_0_1 w0_0_0 w0_0_1 w1_0_0 w1_0_1 dW0_0_0 dW0_0_1 = Gen.adjloop_general_22_g01_d3_299cc2d7fe61 f0 f0_d1 f0_d2 f0_d3 f1 f1_d1 f1_d2 f1_d3 g00 g00_d1 g00_d2 g00_d3 g01 g01_d1 g01_d2 g01_d3 g10 g10_d1 g10_d2 g10_d3 g11 g11_d1 g11_d2 g11_d3 t0 dt theta y0_0_0 y0_0_1 w0_0_0 w0_0_1 w1_0_0 w1_0_1 dW0_0_0 dW0_0_1 from by simp only [Gen.adjloop_general_22_g01_d3_b4420990794d, Gen.adjloop_general_22_g01_d3_299cc2d7fe61, e1, e2, min_self]]
  rw [show Gen.adjloop_general_22_g10_d1_c8bb79da411e f0 f0_d1 f0_d2 f0_d3 f1 f1_d1 f1_d2 f1_d3 g00 g00_d1 g00_d2 g00_d3 g01 g01_d1 g01_d2 g01_d3 g10 g10_d1 g10_d2 g10_d3 g11 g11_d1 g11_d2 g11_d3 t0 dt theta y0_0_0 y0_0_1 w0_0_0 w0_0_1 w1_0_0 w1_0_1 dW0_0_0 dW0_0_1 = Gen.adjloop_general_22_g10_d1_1c1cb23786a4 f0 f0_d1 f0_d2 f0_d3 f1 f1_d1 f1_d2 f1_d3 g00 g00_d1 g00_d2 g00_d3 g01 g01_d1 g01_d2 g01_d3 g10 g10_d1 g10_d2 g10_d3 g11 g11_d1 g11_d2 g11_d3 t0 dt theta y0_0_0 y0_0_1 w0_0_0 w0_0_1 w1_0_0 w1_0_1 dW0_0_0 dW0_0_1 from by simp only [Gen.adjloop_general_22_g10_d1_c8bb79da411e, Gen.adjloop_general_22_g10_d1_1c1cb23786a4, e1, e2, min_self]]
  rw [show Gen.adjloop_general_22_g10_d2_34a16b053e26 f0 f0_d1 f0_d2 f0_d3 f1 f1_d1 f1_d2 f1_d3 g00 g00_d1 g00_d2 g00_d3 g01 g01_d1 g01_d2 g01_d3 g10 g10_d1 g10_d2 g10_d3 g11 g11_d1 g11_d2 g11_d3 t0 dt theta y0_0_0 y0_0_1 w0_0_0 w0_0_1 w1_0_0 w1_0_1 dW0_0_0 dW0_0_1 = Gen.adjloop_general_22_g10_d2_25a870ea714f f0 f0_d1 f0_d2 f0_d3 f1 f1_d1 f1_d2 f1_d3 g00 g00_d1 g00_d2 g00_d3 g01 g01_d1 g01_d2 g01_d3 g10 g10_d1 g10_d2 g10_d3 g11 g11_d1 g11_d2 g11_d3 t0 dt theta y0_0_0 y0_0_1 w0_0_0 w0_0_1 w1_0_0 w1_0_1 dW0_0_0 dW0_0_1 from by simp only [Gen.adjloop_general_22_g10_d2_34a16b053e26, Gen.adjloop_general_22_g10_d2_25a870ea714f, e1, e2, min_self]]
  rw [show Gen.adjloop_general_22_g10_d3_e8e7be1572c3 f0 f0_d1 f0_d2 f0_d3 f1 f1_d1 f1_d2 f1_d3 g00 g00_d1 g00_d2 g00_d3 g01 g01_d1 g01_d2 g01_d3 g10 g10_d1 g10_d2 g10_d3 g11 g11_d1 g11_d2 g11_d3 t0 dt theta y0_0_0 y0_0_1 w0_0_0 w0_0_1 w1_0_0 w1_0_1 dW0_0_0 dW0_0_1 = Gen.adjloop_general_22_g10_d3_764c133efb11 f0 f0_d1 f0_d2 f0_d3 f1 f1_d1 f1_d2 f1_d3 g00 g00_d1 g00_d2 g00_d3 g01 g01_d1 g01_d2 g01_d3 g10 g10_d1 g10_d2 g10_d3 g11 g11_d1 g11_d2 g11_d3 t0 dt theta y0_0_0 y0_0_1 w0_0_0 w0_0_1 w1_0_0 w1_0_1 dW0_0_0 dW0_0_1 from by simp only [Gen.adjloop_general_22_g10_d3_e8e7be1572c3, Gen.adjloop_general_22_g10_d3_764c133efb11, e1, e2, min_self]]
  rw [show Gen.adjloop_general_22_g11_d1_9c3c31565422 f0 f0_d1 f0_d2 f0_d3 f1 f1_d1 f1_d2 f1_d3 g00 g00_d1 g00_d2 g00_d3 g01 g01_d1 g01_d2 g01_d3 g10 g10_d1 g10_d2 g10_d3 g11 g11_d1 g11_d2 g11_d3 t0 dt theta y0_0_0 y0_0_1 w0_0_0 w0_0_1 w1_0_0 w1_0_1 dW0_0_0 dW0_0_1 = Gen.adjloop_general_22_g11_d1_9267b8cca483 f0 f0_d1 f0_d2 f0_d3 f1 f1_d1 f1_d2 f1_d3 g00 g00_d1 g00_d2 g00_d3 g01 g01_d1 g01_d2 g01_d3 g10 g10_d1 g10_d2 g10_d3 g11 g11_d1 g11_d2 g11_d3 t0 dt theta y0_0_0 y0_0_1 w0_0_0 w0_0_1 w1_0_0 w1_0_1 dW0_0_0 dW0_0_1 from by simp only [Gen.adjloop_general_22_g11_d1_9c3c31565422, Gen.adjloop_general_22_g11_d1_9267b8cca483, e1, e2, min_self]]
  rw [show Gen.adjloop_general_22_g11_d2_440c14275e3f f0 f0_d1 f0_d2 f0_d3 f1 f1_d1 f1_d2 f1_d3 g00 g00_d1 g00_d2 g00_d3 g01 g01_d1 g01_d2 g01_d3 g10 g10_d1 g10_d2 g10_d3 g11 g11_d1 g11_d2 g11_d3 t0 dt theta y0_0_0 y0_0_1 w0_0_0 w0_0_1 w1_0_0 w1_0_1 dW0_0_0 dW0_0_1 = Gen.adjloop_general_22_g11_d2_42fcf1b050b9 f0 f0_d1 f0_d2 f0_d3 f1 f1_d1 f1_d2 f1_d3 g00 g00_d1 g00_d2 g00_d3 g01 g01_d1 g01_d2 g01_d3 g10 g10_d1 g10_d2 g10_d3 g11 g11_d1 g11_d2 g11_d3 t0 dt theta y0_0_0 y0_0_1 w0_0_0 w0_0_1 w1_0_0 w1_0_1 dW0_0_0 dW0_0_1 from by simp only [Gen.adjloop_general_22_g11_d2_440c14275e3f, Gen.adjloop_general_22_g11_d2_42fcf1b050b9, e1, e2, min_self]]
  rw [show Gen.adjloop_general_22_g11_d3_d0fa3dc53d2a f0 f0_d1 f0_d2 f0_d3 f1 f1_d1 f1_d2 f1_d3 g00 g00_d1 g00_d2 g00_d3 g01 g01_d1 g01_d2 g01_d3 g10 g10_d1 g10_d2 g10_d3 g11 g11_d1 g11_d2 g11_d3 t0 dt theta y0_0_0 y0_0_1 w0_0_0 w0_0_1 w1_0_0 w1_0_1 dW0_0_0 dW0_0_1 = Gen.adjloop_general_22_g11_d3_8576400b4c48 f0 f0_d1 f0_d2 f0_d3 f1 f1_d1 f1_d2 f1_d3 g00 g00_d1 g00_d2 g00_d3 g01 g01_d1 g01_d2 g01_d3 g10 g10_d1 g10_d2 g10_d3 g11 g11_d1 g11_d2 g11_d3 t0 dt theta y0_0_0 y0_0_1 w0_0_0 w0_0_1 w1_0_0 w1_0_1 dW0_0_0 dW0_0_1 from by simp only [Gen.adjloop_general_22_g11_d3_d0fa3dc53d2a, Gen.adjloop_general_22_g11_d3_8576400b4c48, e1, e2, min_self]]
  try generalize Gen.adjloop_general_22_f0_458d0b220324 f0 f0_d1 f0_d2 f0_d3 f1 f1_d1 f1_d2 f1_d3 g00 g00_d1 g00_d2 g00_d3 g01 g01_d1 g01_d2 g01_d3 g10 g10_d1 g10_d2 g10_d3 g11 g11_d1 g11_d2 g11_d3 t0 dt theta y0_0_0 y0_0_1 w0_0_0 w0_0_1 w1_0_0 w1_0_1 dW0_0_0 dW0_0_1 = a0
  try generalize Gen.adjloop_general_22_f0_8b7b27059830 f0 f0_d1 f0_d2 f0_d3 f1 f1_d1 f1_d2 f1_d3 g00 g00_d1 g00_d2 g00_d3 g01 g01_d1 g01_d2 g01_d3 g10 g10_d1 g10_d2 g10_d3 g11 g11_d1 g11_d2 g11_d3 t0 dt theta y0_0_0 y0_0_1 w0_0_0 w0_0_1 w1_0_0 w1_0_1 dW0_0_0 dW0_0_1 = a1
  try generalize Gen.adjloop_general_22_f0_d1_15634f09b6d9 f0 f0_d1 f0_d2 f0_d3 f1 f1_d1 f1_d2 f1_d3 g00 g00_d1 g00_d2 g00_d3 g01 g01_d1 g01_d2 g01_d3 g10 g10_d1 g10_d2 g10_d3 g11 g11_d1 g11_d2 g11_d3 t0 dt theta y0_0_0 y0_0_1 w0_0_0 w0_0_1 w1_0_0 w1_0_1 dW0_0_0 dW0_0_1 = a2
  try generalize Gen.adjloop_general_22_f0_d1_94e757153f17 f0 f0_d1 f0_d2 f0_d3 f1 f1_d1 f1_d2 f1_d3 g00 g00_d1 g00_d2 g00_d3 g01 g01_d1 g01_d2 g01_d3 g10 g10_d1 g10_d2 g10_d3 g11 g11_d1 g11_d2 g11_d3 t0 dt theta y0_0_0 y0_0_1 w0_0_0 w0_0_1 w1_0_0 w1_0_1 dW0_0_0 dW0_0_1 = a3
  try generalize Gen.adjloop_general_22_f0_d2_7c4c0451e7db f0 f0_d1 f0_d2 f0_d3 f1 f1_d1 f1_d2 f1_d3 g00 g00_d1 g00_d2 g00_d3 g01 g01_d1 g01_d2 g01_d3 g10 g10_d1 g10_d2 g10_d3 g11 g11_d1 g11_d2 g11_d3 t0 dt theta y0_0_0 y0_0_1 w0_0_0 w0_0_1 w1_0_0 w1_0_1 dW0_0_0 dW0_0_1 = a4
  try generalize Gen.adjloop_general_22_f0_d2_7d71de1c3128 f0 f0_d1 f0_d2 f0_d3 f1 f1_d1 f1_d2 f1_d3 g00 g00_d1 g00_d2 g00_d3 g01 g01_d1 g01_d2 g01_d3 g10 g10_d1 g10_d2 g10_d3 g11 g11_d1 g11_d2 g11_d3 t0 dt theta y0_0_0 y0_0_1 w0_0_0 w0_0_1 w1_0_0 w1_0_1 dW0_0_0 dW0_0_1 = a5
  try generalize Gen.adjloop_general_22_f0_d3_05486feaf4e9 f0 f0_d1 f0_d2 f0_d3 f1 f1_d1 f1_d2 f1_d3 g00 g00_d1 g00_d2 g00_d3 g01 g01_d1 g01_d2 g01_d3 g10 g10_d1 g10_d2 g10_d3 g11 g11_d1 g11_d2 g11_d3 t0 dt theta y0_0_0 y0_0_1 w0_0_0 w0_0_1 w1_0_0 w1_0_1 dW0_0_0 dW0_0_1 = a6
  try generalize Gen.adjloop_general_22_f0_d3_71fd194a2007 f0 f0_d1 f0_d2 f0_d3 f1 f1_d1 f1_d2 f1_d3 g00 g00_d1 g00_d2 g00_d3 g01 g01_d1 g01_d2 g01_d3 g10 g10_d1 g10_d2 g10_d3 g11 g11_d1 g11_d2 g11_d3 t0 dt theta y0_0_0 y0_0_1 w0_0_0 w0_0_1 w1_0_0 w1_0_1 dW0_0_0 dW0_0_1 = a7
  try generalize Gen.adjloop_general_22_f0_d3_81cec8de932b f0 f0_d1 f0_d2 f0_d3 f1 f1_d1 f1_d2 f1_d3 g00 g00_d1 g00_d2 g00_d3 g01 g01_d1 g01_d2 g01_d3 g10 g10_d1 g10_d2 g10_d3 g11 g11_d1 g11_d2 g11_d3 t0 dt theta y0_0_0 y0_0_1 w0_0_0 w0_0_1 w1_0_0 w1_0_1 dW0_0_0 dW0_0_1 = a8
  try generalize Gen.adjloop_general_22_f1_17941926937e f0 f0_d1 f0_d2 f0_d3 f1 f1_d1 f1_d2 f1_d3 g00 g00_d1 g00_d2 g00_d3 g01 g01_d1 g01_d2 g01_d3 g10 g10_d1 g10_d2 g10_d3 g11 g11_d1 g11_d2 g11_d3 t0 dt theta y0_0_0 y0_0_1 w0_0_0 w0_0_1 w1_0_0 w1_0_1 dW0_0_0 dW0_0_1 = a9
  try generalize Gen.adjloop_general_22_f1_7c0be7f7fbb3 f0 f0_d1 f0_d2 f0_d3 f1 f1_d1 f1_d2 f1_d3 g00 g00_d1 g00_d2 g00_d3 g01 g01_d1 g01_d2 g01_d3 g10 g10_d1 g10_d2 g10_d3 g11 g11_d1 g11_d2 g11_d3 t0 dt theta y0_0_0 y0_0_1 w0_0_0 w0_0_1 w1_0_0 w1_0_1 dW0_0_0 dW0_0_1 = a10
  try generalize Gen.adjloop_general_22_f1_d1_d0ac0737681b f0 f0_d1 f0_d2 f0_d3 f1 f1_d1 f1_d2 f1_d3 g00 g00_d1 g00_d2 g00_d3 g01 g01_d1 g01_d2 g01_d3 g10 g10_d1 g10_d2 g10_d3 g11 g11_d1 g11_d2 g11_d3 t0 dt theta y0_0_0 y0_0_1 w0_0_0 w0_0_1 w1_0_0 w1_0_1 dW0_0_0 dW0_0_1 = a11
  try generalize Gen.adjloop_general_22_f1_d1_e3739d2f150a f0 f0_d1 f0_d2 f0_d3 f1 f1_d1 f1_d2 f1_d3 g00 g00_d1 g00_d2 g00_d3 g01 g01_d1 g01_d2 g01_d3 g10 g10_d1 g10_d2 g10_d3 g11 g11_d1 g11_d2 g11_d3 t0 dt theta y0_0_0 y0_0_1 w0_0_0 w0_0_1 w1_0_0 w1_0_1 dW0_0_0 dW0_0_1 = a12
  try generalize Gen.adjloop_general_22_f1_d2_43511aa619c2 f0 f0_d1 f0_d2 f0_d3 f1 f1_d1 f1_d2 f1_d3 g00 g00_d1 g00_d2 g00_d3 g01 g01_d1 g01_d2 g01_d3 g10 g10_d1 g10_d2 g10_d3 g11 g11_d1 g11_d2 g11_d3 t0 dt theta y0_0_0 y0_0_1 w0_0_0 w0_0_1 w1_0_0 w1_0_1 dW0_0_0 dW0_0_1 = a13
  try generalize Gen.adjloop_general_22_f1_d2_ff5e7643cd13 f0 f0_d1 f0_d2 f0_d3 f1 f1_d1 f1_d2 f1_d3 g00 g00_d1 g00_d2 g00_d3 g01 g01_d1 g01_d2 g01_d3 g10 g10_d1 g10_d2 g10_d3 g11 g11_d1 g11_d2 g11_d3 t0 dt theta y0_0_0 y0_0_1 w0_0_0 w0_0_1 w1_0_0 w1_0_1 dW0_0_0 dW0_0_1 = a14
  try generalize Gen.adjloop_general_22_f1_d3_19ddc0b1cd8d f0 f0_d1 f0_d2 f0_d3 f1 f1_d1 f1_d2 f1_d3 g00 g00_d1 g00_d2 g00_d3 g01 g01_d1 g01_d2 g01_d3 g10 g10_d1 g10_d2 g10_d3 g11 g11_d1 g11_d2 g11_d3 t0 dt theta y0_0_0 y0_0_1 w0_0_0 w0_0_1 w1_0_0 w1_0_1 dW0_0_0 dW0_0_1 = a15
  try generalize Gen.adjloop_general_22_f1_d3_af71255d8127 f0 f0_d1 f0_d2 f0_d3 f1 f1_d1 f1_d2 f1_d3 g00 g00_d1 g00_d2 g00_d3 g01 g01_d1 g01_d2 g01_d3 g10 g10_d1 g10_d2 g10_d3 g11 g11_d1 g11_d2 g11_d3 t0 dt theta y0_0_0 y0_0_1 w0_0_0 w0_0_1 w1_0_0 w1_0_1 dW0_0_0 dW0_0_1 = a16
  try generalize Gen.adjloop_general_22_f1_d3_f4e7587a9efa f0 f0_d1 f0_d2 f0_d3 f1 f1_d1 f1_d2 f1_d3 g00 g00_d1 g00_d2 g00_d3 g01 g01_d1 g01_d2 g01_d3 g10 g10_d1 g10_d2 g10_d3 g11 g11_d1 g11_d2 g11_d3 t0 dt theta y0_0_0 y0_0_1 w0_0_0 w0_0_1 w1_0_0 w1_0_1 dW0_0_0 dW0_0_1 = a17
  try generalize Gen.adjloop_general_22_g00_462e2db3a013 f0 f0_d1 f0_d2 f0_d3 f1 f1_d1 f1_d2 f1_d3 g00 g00_d1 g00_d2 g00_d3 g01 g01_d1 g01_d2 g01_d3 g10 g10_d1 g10_d2 g10_d3 g11 g11_d1 g11_d2 g11_d3 t0 dt theta y0_0_0 y0_0_1 w0_0_0 w0_0_1 w1_0_0 w1_0_1 dW0_0_0 dW0_0_1 = a18
  try generalize Gen.adjloop_general_22_g00_9e18be45a5ce f0 f0_d1 f0_d2 f0_d3 f1 f1_d1 f1_d2 f1_d3 g00 g00_d1 g00_d2 g00_d3 g01 g01_d1 g01_d2 g01_d3 g10 g10_d1 g10_d2 g10_d3 g11 g11_d1 g11_d2 g11_d3 t0 dt theta y0_0_0 y0_0_1 w0_0_0 w0_0_1 w1_0_0 w1_0_1 dW0_0_0 dW0_0_1 = a19
  try generalize Gen.adjloop_general_22_g00_d1_0e0ed7f41a61 f0 f0_d1 f0_d2 f0_d3 f1 f1_d1 f1_d2 f1_d3 g00 g00_d1 g00_d2 g00_d3 g01 g01_d1 g01_d2 g01_d3 g10 g10_d1 g10_d2 g10_d3 g11 g11_d1 g11_d2 g11_d3 t0 dt theta y0_0_0 y0_0_1 w0_0_0 w0_0_1 w1_0_0 w1_0_1 dW0_0_0 dW0_0_1 = a20
  try generalize Gen.adjloop_general_22_g00_d1_fb59be7d66fa f0 f0_d1 f0_d2 f0_d3 f1 f1_d1 f1_d2 f1_d3 g00 g00_d1 g00_d2 g00_d3 g01 g01_d1 g01_d2 g01_d3 g10 g10_d1 g10_d2 g10_d3 g11 g11_d1 g11_d2 g11_d3 t0 dt theta y0_0_0 y0_0_1 w0_0_0 w0_0_1 w1_0_0 w1_0_1 dW0_0_0 dW0_0_1 = a21
  try generalize Gen.adjloop_general_22_g00_d2_292668480761 f0 f0_d1 f0_d2 f0_d3 f1 f1_d1 f1_d2 f1_d3 g00 g00_d1 g00_d2 g00_d3 g01 g01_d1 g01_d2 g01_d3 g10 g10_d1 g10_d2 g10_d3 g11 g11_d1 g11_d2 g11_d3 t0 dt theta y0_0_0 y0_0_1 w0_0_0 w0_0_1 w1_0_0 w1_0_1 dW0_0_0 dW0_0_1 = a22
  try generalize Gen.adjloop_general_22_g00_d2_e26ff264c485 f0 f0_d1 f0_d2 f0_d3 f1 f1_d1 f1_d2 f1_d3 g00 g00_d1 g00_d2 g00_d3 g01 g01_d1 g01_d2 g01_d3 g10 g10_d1 g10_d2 g10_d3 g11 g11_d1 g11_d2 g11_d3 t0 dt theta y0_0_0 y0_0_1 w0_0_0 w0_0_1 w1_0_0 w1_0_1 dW0_0_0 dW0_0_1 = a23
  try generalize Gen.adjloop_general_22_g00_d3_bdcaed58cf32 f0 f0_d1 f0_d2 f0_d3 f1 f1_d1 f1_d2 f1_d3 g00 g00_d1 g00_d2 g00_d3 g01 g01_d1 g01_d2 g01_d3 g10 g10_d1 g10_d2 g10_d3 g11 g11_d1 g11_d2 g11_d3 t0 dt theta y0_0_0 y0_0_1 w0_0_0 w0_0_1 w1_0_0 w1_0_1 dW0_0_0 dW0_0_1 = a24
  try generalize Gen.adjloop_general_22_g00_d3_c0d7ecb7334e f0 f0_d1 f0_d2 f0_d3 f1 f1_d1 f1_d2 f1_d3 g00 g00_d1 g00_d2 g00_d3 g01 g01_d1 g01_d2 g01_d3 g10 g10_d1 g10_d2 g10_d3 g11 g11_d1 g11_d2 g11_d3 t0 dt theta y0_0_0 y0_0_1 w0_0_0 w0_0_1 w1_0_0 w1_0_1 dW0_0_0 dW0_0_1 = a25
  try generalize Gen.adjloop_general_22_g00_d3_ea35ffaa17b4 f0 f0_d1 f0_d2 f0_d3 f1 f1_d1 f1_d2 f1_d3 g00 g00_d1 g00_d2 g00_d3 g01 g01_d1 g01_d2 g01_d3 g10 g10_d1 g10_d2 g10_d3 g11 g11_d1 g11_d2 g11_d3 t0 dt theta y0_0_0 y0_0_1 w0_0_0 w0_0_1 w1_0_0 w1_0_1 dW0_0_0 dW0_0_1 = a26
  try generalize Gen.adjloop_general_22_g01_8f73612fb0d7 f0 f0_d1 f0_d2 f0_d3 f1 f1_d1 f1_d2 f1_d3 g00 g00_d1 g00_d2 g00_d3 g01 g01_d1 g01_d2 g01_d3 g10 g10_d1 g10_d2 g10_d3 g11 g11_d1 g11_d2 g11_d3 t0 dt theta y0_0_0 y0_0_1 w0_0_0 w0_0_1 w1_0_0 w1_0_1 dW0_0_0 dW0_0_1 = a27
  try generalize Gen.adjloop_general_22_g01_b8238ff245ae f0 f0_d1 f0_d2 f0_d3 f1 f1_d1 f1_d2 f1_d3 g00 g00_d1 g00_d2 g00_d3 g01 g01_d1 g01_d2 g01_d3 g10 g10_d1 g10_d2 g10_d3 g11 g11_d1 g11_d2 g11_d3 t0 dt theta y0_0_0 y0_0_1 w0_0_0 w0_0_1 w1_0_0 w1_0_1 dW0_0_0 dW0_0_1 = a28
  try generalize Gen.adjloop_general_22_g01_d1_004f124a13cb f0 f0_d1 f0_d2 f0_d3 f1 f1_d1 f1_d2 f1_d3 g00 g00_d1 g00_d2 g00_d3 g01 g01_d1 g01_d2 g01_d3 g10 g10_d1 g10_d2 g10_d3 g11 g11_d1 g11_d2 g11_d3 t0 dt theta y0_0_0 y0_0_1 w0_0_0 w0_0_1 w1_0_0 w1_0_1 dW0_0_0 dW0_0_1 = a29
  try generalize Gen.adjloop_general_22_g01_d1_91fbfbc93063 f0 f0_d1 f0_d2 f0_d3 f1 f1_d1 f1_d2 f1_d3 g00 g00_d1 g00_d2 g00_d3 g01 g01_d1 g01_d2 g01_d3 g10 g10_d1 g10_d2 g10_d3 g11 g11_d1 g11_d2 g11_d3 t0 dt theta y0_0_0 y0_0_1 w0_0_0 w0_0_1 w1_0_0 w1_0_1 dW0_0_0 dW0_0_1 = a30
  try generalize Gen.adjloop_general_22_g01_d2_6aaf1b3e33ff f0 f0_d1 f0_d2 f0_d3 f1 f1_d1 f1_d2 f1_d3 g00 g00_d1 g00_d2 g00_d3 g01 g01_d1 g01_d2 g01_d3 g10 g10_d1 g10_d2 g10_d3 g11 g11_d1 g11_d2 g11_d3 t0 dt theta y0_0_0 y0_0_1 w0_0_0 w0_0_1 w1_0_0 w1_0_1 dW0_0_0 dW0_0_1 = a31
  try generalize Gen.adjloop_general_22_g01_d2_d4258cf3199e f0 f0_d1 f0_d2 f0_d3 f1 f1_d1 f1_d2 f1_d3 g00 g00_d1 g00_d2 g00_d3 g01 g01_d1 g01_d2 g01_d3 g10 g10_d1 g10_d2 g10_d3 g11 g11_d1 g11_d2 g11_d3 t0 dt theta y0_0_0 y0_0_1 w0_0_0 w0_0_1 w1_0_0 w1_0_1 dW0_0_0 dW0_0_1 = a32
  try generalize Gen.adjloop_general_22_g01_d3_299cc2d7fe61 f0 f0_d1 f0_d2 f0_d3 f1 f1_d1 f1_d2 f1_d3 g00 g00_d1 g00_d2 g00_d3 g01 g01_d1 g01_d2 g01_d3 g10 g10_d1 g10_d2 g10_d3 g11 g11_d1 g11_d2 g11_d3 t0 dt theta y0_0_0 y0_0_1 w0_0_0 w0_0_1 w1_0_0 w1_0_1 dW0_0_0 dW0_0_1 = a33
  try generalize Gen.adjloop_general_22_g01_d3_49787cdc62bf f0 f0_d1 f0_d2 f0_d3 f1 f1_d1 f1_d2 f1_d3 g00 g00_d1 g00_d2 g00_d3 g01 g01_d1 g01_d2 g01_d3 g10 g10_d1 g10_d2 g10_d3 g11 g11_d1 g11_d2 g11_d3 t0 dt theta y0_0_0 y0_0_1 w0_0_0 w0_0_1 w1_0_0 w1_0_1 dW0_0_0 dW0_0_1 = a34
  try generalize Gen.adjloop_general_22_g01_d3_b4420990794d f0 f0_d1 f0_d2 f0_d3 f1 f1_d1 f1_d2 f1_d3 g00 g00_d1 g00_d2 g00_d3 g01 g01_d1 g01_d2 g01_d3 g10 g10_d1 g10_d2 g10_d3 g11 g11_d1 g11_d2 g11_d3 t0 dt theta y0_0_0 y0_0_1 w0_0_0 w0_0_1 w1_0_0 w1_0_1 dW0_0_0 dW0_0_1 = a35
  try generalize Gen.adjloop_general_22_g10_cc8ea48e41b6 f0 f0_d1 f0_d2 f0_d3 f1 f1_d1 f1_d2 f1_d3 g00 g00_d1 g00_d2 g00_d3 g01 g01_d1 g01_d2 g01_d3 g10 g10_d1 g10_d2 g10_d3 g11 g11_d1 g11_d2 g11_d3 t0 dt theta y0_0_0 y0_0_1 w0_0_0 w0_0_1 w1_0_0 w1_0_1 dW0_0_0 dW0_0_1 = a36
  try generalize Gen.adjloop_general_22_g10_d1_1c1cb23786a4 f0 f0_d1 f0_d2 f0_d3 f1 f1_d1 f1_d2 f1_d3 g00 g00_d1 g00_d2 g00_d3 g01 g01_d1 g01_d2 g01_d3 g10 g10_d1 g10_d2 g10_d3 g11 g11_d1 g11_d2 g11_d3 t0 dt theta y0_0_0 y0_0_1 w0_0_0 w0_0_1 w1_0_0 w1_0_1 dW0_0_0 dW0_0_1 = a37
  try generalize Gen.adjloop_general_22_g10_d1_c8bb79da411e f0 f0_d1 f0_d2 f0_d3 f1 f1_d1 f1_d2 f1_d3 g00 g00_d1 g00_d2 g00_d3 g01 g01_d1 g01_d2 g01_d3 g10 g10_d1 g10_d2 g10_d3 g11 g11_d1 g11_d2 g11_d3 t0 dt theta y0_0_0 y0_0_1 w0_0_0 w0_0_1 w1_0_0 w1_0_1 dW0_0_0 dW0_0_1 = a38
  try generalize Gen.adjloop_general_22_g10_d2_25a870ea714f f0 f0_d1 f0_d2 f0_d3 f1 f1_d1 f1_d2 f1_d3 g00 g00_d1 g00_d2 g00_d3 g01 g01_d1 g01_d2 g01_d3 g10 g10_d1 g10_d2 g10_d3 g11 g11_d1 g11_d2 g11_d3 t0 dt theta y0_0_0 y0_0_1 w0_0_0 w0_0_1 w1_0_0 w1_0_1 dW0_0_0 dW0_0_1 = a39
  try generalize Gen.adjloop_general_22_g10_d2_34a16b053e26 f0 f0_d1 f0_d2 f0_d3 f1 f1_d1 f1_d2 f1_d3 g00 g00_d1 g00_d2 g00_d3 g01 g01_d1 g01_d2 g01_d3 g10 g10_d1 g10_d2 g10_d3 g11 g11_d1 g11_d2 g11_d3 t0 dt theta y0_0_0 y0_0_1 w0_0_0 w0_0_1 w1_0_0 w1_0_1 dW0_0_0 dW0_0_1 = a40
  try generalize Gen.adjloop_general_22_g10_d3_05ff9735d07f f0 f0_d1 f0_d2 f0_d3 f1 f1_d1 f1_d2 f1_d3 g00 g00_d1 g00_d2 g00_d3 g01 g01_d1 g01_d2 g01_d3 g10 g10_d1 g10_d2 g10_d3 g11 g11_d1 g11_d2 g11_d3 t0 dt theta y0_0_0 y0_0_1 w0_0_0 w0_0_1 w1_0_0 w1_0_1 dW0_0_0 dW0_0_1 = a41
  try generalize Gen.adjloop_general_22_g10_d3_764c133efb11 f0 f0_d1 f0_d2 f0_d3 f1 f1_d1 f1_d2 f1_d3 g00 g00_d1 g00_d2 g00_d3 g01 g01_d1 g01_d2 g01_d3 g10 g10_d1 g10_d2 g10_d3 g11 g11_d1 g11_d2 g11_d3 t0 dt theta y0_0_0 y0_0_1 w0_0_0 w0_0_1 w1_0_0 w1_0_1 dW0_0_0 dW0_0_1 = a42
  try generalize Gen.adjloop_general_22_g10_d3_e8e7be1572c3 f0 f0_d1 f0_d2 f0_d3 f1 f1_d1 f1_d2 f1_d3 g00 g00_d1 g00_d2 g00_d3 g01 g01_d1 g01_d2 g01_d3 g10 g10_d1 g10_d2 g10_d3 g11 g11_d1 g11_d2 g11_d3 t0 dt theta y0_0_0 y0_0_1 w0_0_0 w0_0_1 w1_0_0 w1_0_1 dW0_0_0 dW0_0_1 = a43
  try generalize Gen.adjloop_general_22_g10_dd89bcb9088f f0 f0_d1 f0_d2 f0_d3 f1 f1_d1 f1_d2 f1_d3 g00 g00_d1 g00_d2 g00_d3 g01 g01_d1 g01_d2 g01_d3 g10 g10_d1 g10_d2 g10_d3 g11 g11_d1 g11_d2 g11_d3 t0 dt theta y0_0_0 y0_0_1 w0_0_0 w0_0_1 w1_0_0 w1_0_1 dW0_0_0 dW0_0_1 = a44
  try generalize Gen.adjloop_general_22_g11_0908a869832b f0 f0_d1 f0_d2 f0_d3 f1 f1_d1 f1_d2 f1_d3 g00 g00_d1 g00_d2 g00_d3 g01 g01_d1 g01_d2 g01_d3 g10 g10_d1 g10_d2 g10_d3 g11 g11_d1 g11_d2 g11_d3 t0 dt theta y0_0_0 y0_0_1 w0_0_0 w0_0_1 w1_0_0 w1_0_1 dW0_0_0 dW0_0_1 = a45
  try generalize Gen.adjloop_general_22_g11_7674affb00fc f0 f0_d1 f0_d2 f0_d3 f1 f1_d1 f1_d2 f1_d3 g00 g00_d1 g00_d2 g00_d3 g01 g01_d1 g01_d2 g01_d3 g10 g10_d1 g10_d2 g10_d3 g11 g11_d1 g11_d2 g11_d3 t0 dt theta y0_0_0 y0_0_1 w0_0_0 w0_0_1 w1_0_0 w1_0_1 dW0_0_0 dW0_0_1 = a46
  try generalize Gen.adjloop_general_22_g11_d1_9267b8cca483 f0 f0_d1 f0_d2 f0_d3 f1 f1_d1 f1_d2 f1_d3 g00 g00_d1 g00_d2 g00_d3 g01 g01_d1 g01_d2 g01_d3 g10 g10_d1 g10_d2 g10_d3 g11 g11_d1 g11_d2 g11_d3 t0 dt theta y0_0_0 y0_0_1 w0_0_0 w0_0_1 w1_0_0 w1_0_1 dW0_0_0 dW0_0_1 = a47
  try generalize Gen.adjloop_general_22_g11_d1_9c3c31565422 f0 f0_d1 f0_d2 f0_d3 f1 f1_d1 f1_d2 f1_d3 g00 g00_d1 g00_d2 g00_d3 g01 g01_d1 g01_d2 g01_d3 g10 g10_d1 g10_d2 g10_d3 g11 g11_d1 g11_d2 g11_d3 t0 dt theta y0_0_0 y0_0_1 w0_0_0 w0_0_1 w1_0_0 w1_0_1 dW0_0_0 dW0_0_1 = a48
  try generalize Gen.adjloop_general_22_g11_d2_42fcf1b050b9 f0 f0_d1 f0_d2 f0_d3 f1 f1_d1 f1_d2 f1_d3 g00 g00_d1 g00_d2 g00_d3 g01 g01_d1 g01_d2 g01_d3 g10 g10_d1 g10_d2 g10_d3 g11 g11_d1 g11_d2 g11_d3 t0 dt theta y0_0_0 y0_0_1 w0_0_0 w0_0_1 w1_0_0 w1_0_1 dW0_0_0 dW0_0_1 = a49
  try generalize Gen.adjloop_general_22_g11_d2_440c14275e3f f0 f0_d1 f0_d2 f0_d3 f1 f1_d1 f1_d2 f1_d3 g00 g00_d1 g00_d2 g00_d3 g01 g01_d1 g01_d2 g01_d3 g10 g10_d1 g10_d2 g10_d3 g11 g11_d1 g11_d2 g11_d3 t0 dt theta y0_0_0 y0_0_1 w0_0_0 w0_0_1 w1_0_0 w1_0_1 dW0_0_0 dW0_0_1 = a50
  try generalize Gen.adjloop_general_22_g11_d3_6d5d3995bf7b f0 f0_d1 f0_d2 f0_d3 f1 f1_d1 f1_d2 f1_d3 g00 g00_d1 g00_d2 g00_d3 g01 g01_d1 g01_d2 g01_d3 g10 g10_d1 g10_d2 g10_d3 g11 g11_d1 g11_d2 g11_d3 t0 dt theta y0_0_0 y0_0_1 w0_0_0 w0_0_1 w1_0_0 w1_0_1 dW0_0_0 dW0_0_1 = a51
  try generalize Gen.adjloop_general_22_g11_d3_8576400b4c48 f0 f0_d1 f0_d2 f0_d3 f1 f1_d1 f1_d2 f1_d3 g00 g00_d1 g00_d2 g00_d3 g01 g01_d1 g01_d2 g01_d3 g10 g10_d1 g10_d2 g10_d3 g11 g11_d1 g11_d2 g11_d3 t0 dt theta y0_0_0 y0_0_1 w0_0_0 w0_0_1 w1_0_0 w1_0_1 dW0_0_0 dW0_0_1 = a52
  try generalize Gen.adjloop_general_22_g11_d3_d0fa3dc53d2a f0 f0_d1 f0_d2 f0_d3 f1 f1_d1 f1_d2 f1_d3 g00 g00_d1 g00_d2 g00_d3 g01 g01_d1 g01_d2 g01_d3 g10 g10_d1 g10_d2 g10_d3 g11 g11_d1 g11_d2 g11_d3 t0 dt theta y0_0_0 y0_0_1 w0_0_0 w0_0_1 w1_0_0 w1_0_1 dW0_0_0 dW0_0_1 = a53
  try (first | ring | (field_simp; ring))

end C09Loop
