/-
C08 — sdeint is differentiable: backprop equals the derivative of the numerical solution (fixed steps).

WRITTEN BY vlib/author_c08.py; COMMITTED; re-checked against lean/Tsv/Gen/Grad.lean, which is regenerated on every run by tracing,
for every solver x noise type, TWO fixed steps of the real `BaseSDESolver.integrate` (second step clipped to `ts[-1]`, output
produced by the real `linear_interp`) on a user SDE `f(t, y, θ)`, `g(t, y, θ)` with uninterpreted `f`, `g`, and then

  g…  : `torch.autograd.grad(yT, [y0, θ], grad_outputs = v)` executed on the TRACED GRAPH with torch's semantics (requires_grad
        propagation, `detach`, `create_graph`, `enable_grad` / `no_grad` blocks exactly as the library wrote them; the partial
        derivatives of `f`, `g` are the symbols `f_d1` (∂/∂y), `f_d2` (∂/∂θ), `g_d11`, … the tracer introduces),
  t…  : `v · ∂yT/∂y0`, `v · ∂yT/∂θ` obtained by forward differentiation of the VALUE (arithmetic only: blind to detach etc.).

Theorem per program: `g… = t…` for ARBITRARY `f`, `g`, their derivative symbols, state, parameter, increments, cotangent —
so nothing on the path from `(y0, θ)` to the output is detached or computed without a graph: solvers that differentiate the
diffusion internally (Milstein's `g ∂g v` via `vjp(create_graph=…)`, log-ODE's double-backward `jvp`) included.
Both sides are validated against the real `torch.autograd.grad` on every run (translation validation).
-/
import Tsv.Gen.Grad
import Mathlib.Tactic.Ring

namespace C08
set_option linter.unusedSectionVars false
set_option linter.unusedVariables false
set_option linter.unusedTactic false
set_option linter.unreachableTactic false
set_option maxRecDepth 8000
variable {K : Type} [Field K] [LinearOrder K]


set_option maxHeartbeats 4000000 in
/-- `gradp_euler_i_additive_11`: backprop `gth` = forward derivative `tth` -/
theorem gradp_euler_i_additive_11_gth  (f : K → K → K → K) (f_d1 : K → K → K → K) (f_d2 : K → K → K → K) (g : K → K → K) (g_d1 : K → K → K) (t0 t2 dt y0_0_0 theta v_0_0 dW0_0_0 dW1_0_0 : K) :
    Gen.gradp_euler_i_additive_11_gth f f_d1 f_d2 g g_d1 t0 t2 dt y0_0_0 theta v_0_0 dW0_0_0 dW1_0_0 = Gen.gradp_euler_i_additive_11_tth f f_d1 f_d2 g g_d1 t0 t2 dt y0_0_0 theta v_0_0 dW0_0_0 dW1_0_0 := by
  simp only [Gen.gradp_euler_i_additive_11_gth, Gen.gradp_euler_i_additive_11_tth]
  generalize Gen.gradp_euler_i_additive_11_f_d1_9c7524f038aa f f_d1 f_d2 g g_d1 t0 t2 dt y0_0_0 theta v_0_0 dW0_0_0 dW1_0_0 = a0
  generalize Gen.gradp_euler_i_additive_11_f_d2_4894b01bac57 f f_d1 f_d2 g g_d1 t0 t2 dt y0_0_0 theta v_0_0 dW0_0_0 dW1_0_0 = a1
  generalize Gen.gradp_euler_i_additive_11_f_d2_75ad011491cf f f_d1 f_d2 g g_d1 t0 t2 dt y0_0_0 theta v_0_0 dW0_0_0 dW1_0_0 = a2
  generalize Gen.gradp_euler_i_additive_11_g_d1_39aaf857762f f f_d1 f_d2 g g_d1 t0 t2 dt y0_0_0 theta v_0_0 dW0_0_0 dW1_0_0 = a3
  generalize Gen.gradp_euler_i_additive_11_g_d1_3d49352567ba f f_d1 f_d2 g g_d1 t0 t2 dt y0_0_0 theta v_0_0 dW0_0_0 dW1_0_0 = a4
  ring

set_option maxHeartbeats 4000000 in
/-- `gradp_milstein_i_diagonal_11`: backprop `gth` = forward derivative `tth` -/
theorem gradp_milstein_i_diagonal_11_gth  (f : K → K → K → K) (f_d1 : K → K → K → K) (f_d2 : K → K → K → K) (g : K → K → K → K) (g_d1 : K → K → K → K) (g_d11 : K → K → K → K) (g_d12 : K → K → K → K) (g_d2 : K → K → K → K) (t0 t2 dt y0_0_0 theta v_0_0 dW0_0_0 dW1_0_0 : K) :
    Gen.gradp_milstein_i_diagonal_11_gth f f_d1 f_d2 g g_d1 g_d11 g_d12 g_d2 t0 t2 dt y0_0_0 theta v_0_0 dW0_0_0 dW1_0_0 = Gen.gradp_milstein_i_diagonal_11_tth f f_d1 f_d2 g g_d1 g_d11 g_d12 g_d2 t0 t2 dt y0_0_0 theta v_0_0 dW0_0_0 dW1_0_0 := by
  simp only [Gen.gradp_milstein_i_diagonal_11_gth, Gen.gradp_milstein_i_diagonal_11_tth]
  generalize Gen.gradp_milstein_i_diagonal_11_f_d1_489ec9895782 f f_d1 f_d2 g g_d1 g_d11 g_d12 g_d2 t0 t2 dt y0_0_0 theta v_0_0 dW0_0_0 dW1_0_0 = a0
  generalize Gen.gradp_milstein_i_diagonal_11_f_d2_75ad011491cf f f_d1 f_d2 g g_d1 g_d11 g_d12 g_d2 t0 t2 dt y0_0_0 theta v_0_0 dW0_0_0 dW1_0_0 = a1
  generalize Gen.gradp_milstein_i_diagonal_11_f_d2_f1a1d483eb7a f f_d1 f_d2 g g_d1 g_d11 g_d12 g_d2 t0 t2 dt y0_0_0 theta v_0_0 dW0_0_0 dW1_0_0 = a2
  generalize Gen.gradp_milstein_i_diagonal_11_g_70f35061c2d0 f f_d1 f_d2 g g_d1 g_d11 g_d12 g_d2 t0 t2 dt y0_0_0 theta v_0_0 dW0_0_0 dW1_0_0 = a3
  generalize Gen.gradp_milstein_i_diagonal_11_g_d11_8064c5c39114 f f_d1 f_d2 g g_d1 g_d11 g_d12 g_d2 t0 t2 dt y0_0_0 theta v_0_0 dW0_0_0 dW1_0_0 = a4
  generalize Gen.gradp_milstein_i_diagonal_11_g_d12_40f4a140374f f f_d1 f_d2 g g_d1 g_d11 g_d12 g_d2 t0 t2 dt y0_0_0 theta v_0_0 dW0_0_0 dW1_0_0 = a5
  generalize Gen.gradp_milstein_i_diagonal_11_g_d12_f09e45d90827 f f_d1 f_d2 g g_d1 g_d11 g_d12 g_d2 t0 t2 dt y0_0_0 theta v_0_0 dW0_0_0 dW1_0_0 = a6
  generalize Gen.gradp_milstein_i_diagonal_11_g_d1_ddd0c5e556e2 f f_d1 f_d2 g g_d1 g_d11 g_d12 g_d2 t0 t2 dt y0_0_0 theta v_0_0 dW0_0_0 dW1_0_0 = a7
  generalize Gen.gradp_milstein_i_diagonal_11_g_d1_f7710a2eb195 f f_d1 f_d2 g g_d1 g_d11 g_d12 g_d2 t0 t2 dt y0_0_0 theta v_0_0 dW0_0_0 dW1_0_0 = a8
  generalize Gen.gradp_milstein_i_diagonal_11_g_d2_1dbf2324c025 f f_d1 f_d2 g g_d1 g_d11 g_d12 g_d2 t0 t2 dt y0_0_0 theta v_0_0 dW0_0_0 dW1_0_0 = a9
  generalize Gen.gradp_milstein_i_diagonal_11_g_d2_722b7a6bbfae f f_d1 f_d2 g g_d1 g_d11 g_d12 g_d2 t0 t2 dt y0_0_0 theta v_0_0 dW0_0_0 dW1_0_0 = a10
  generalize Gen.gradp_milstein_i_diagonal_11_g_db15086d257d f f_d1 f_d2 g g_d1 g_d11 g_d12 g_d2 t0 t2 dt y0_0_0 theta v_0_0 dW0_0_0 dW1_0_0 = a11
  ring

set_option maxHeartbeats 4000000 in
/-- `grad_milstein_i_scalar_11_gf`: backprop `gth` = forward derivative `tth` -/
theorem grad_milstein_i_scalar_11_gf_gth (sqrt : K → K) (f : K → K → K → K) (f_d1 : K → K → K → K) (f_d2 : K → K → K → K) (g : K → K → K → K) (g_d1 : K → K → K → K) (g_d2 : K → K → K → K) (t0 t2 dt y0_0_0 theta v_0_0 dW0_0_0 dW1_0_0 : K) :
    Gen.grad_milstein_i_scalar_11_gf_gth sqrt f f_d1 f_d2 g g_d1 g_d2 t0 t2 dt y0_0_0 theta v_0_0 dW0_0_0 dW1_0_0 = Gen.grad_milstein_i_scalar_11_gf_tth sqrt f f_d1 f_d2 g g_d1 g_d2 t0 t2 dt y0_0_0 theta v_0_0 dW0_0_0 dW1_0_0 := by
  simp only [Gen.grad_milstein_i_scalar_11_gf_gth, Gen.grad_milstein_i_scalar_11_gf_tth]
  generalize Gen.grad_milstein_i_scalar_11_gf_f_d1_0d13626a177a sqrt f f_d1 f_d2 g g_d1 g_d2 t0 t2 dt y0_0_0 theta v_0_0 dW0_0_0 dW1_0_0 = a0
  generalize Gen.grad_milstein_i_scalar_11_gf_f_d2_75ad011491cf sqrt f f_d1 f_d2 g g_d1 g_d2 t0 t2 dt y0_0_0 theta v_0_0 dW0_0_0 dW1_0_0 = a1
  generalize Gen.grad_milstein_i_scalar_11_gf_f_d2_8f01485f34bd sqrt f f_d1 f_d2 g g_d1 g_d2 t0 t2 dt y0_0_0 theta v_0_0 dW0_0_0 dW1_0_0 = a2
  generalize Gen.grad_milstein_i_scalar_11_gf_g_d1_02b813f80bf9 sqrt f f_d1 f_d2 g g_d1 g_d2 t0 t2 dt y0_0_0 theta v_0_0 dW0_0_0 dW1_0_0 = a3
  generalize Gen.grad_milstein_i_scalar_11_gf_g_d1_fcbd887f1bc8 sqrt f f_d1 f_d2 g g_d1 g_d2 t0 t2 dt y0_0_0 theta v_0_0 dW0_0_0 dW1_0_0 = a4
  generalize Gen.grad_milstein_i_scalar_11_gf_g_d1_fe90e523b752 sqrt f f_d1 f_d2 g g_d1 g_d2 t0 t2 dt y0_0_0 theta v_0_0 dW0_0_0 dW1_0_0 = a5
  generalize Gen.grad_milstein_i_scalar_11_gf_g_d2_30df7870a577 sqrt f f_d1 f_d2 g g_d1 g_d2 t0 t2 dt y0_0_0 theta v_0_0 dW0_0_0 dW1_0_0 = a6
  generalize Gen.grad_milstein_i_scalar_11_gf_g_d2_5f1ed0e1d509 sqrt f f_d1 f_d2 g g_d1 g_d2 t0 t2 dt y0_0_0 theta v_0_0 dW0_0_0 dW1_0_0 = a7
  generalize Gen.grad_milstein_i_scalar_11_gf_g_d2_722b7a6bbfae sqrt f f_d1 f_d2 g g_d1 g_d2 t0 t2 dt y0_0_0 theta v_0_0 dW0_0_0 dW1_0_0 = a8
  generalize Gen.grad_milstein_i_scalar_11_gf_g_d2_9c51f97a67da sqrt f f_d1 f_d2 g g_d1 g_d2 t0 t2 dt y0_0_0 theta v_0_0 dW0_0_0 dW1_0_0 = a9
  ring

set_option maxHeartbeats 4000000 in
/-- `grad_milstein_i_scalar_11_gf`: backprop `gy_0_0` = forward derivative `ty_0_0` -/
theorem grad_milstein_i_scalar_11_gf_gy_0_0 (sqrt : K → K) (f : K → K → K → K) (f_d1 : K → K → K → K) (f_d2 : K → K → K → K) (g : K → K → K → K) (g_d1 : K → K → K → K) (g_d2 : K → K → K → K) (t0 t2 dt y0_0_0 theta v_0_0 dW0_0_0 dW1_0_0 : K) :
    Gen.grad_milstein_i_scalar_11_gf_gy_0_0 sqrt f f_d1 f_d2 g g_d1 g_d2 t0 t2 dt y0_0_0 theta v_0_0 dW0_0_0 dW1_0_0 = Gen.grad_milstein_i_scalar_11_gf_ty_0_0 sqrt f f_d1 f_d2 g g_d1 g_d2 t0 t2 dt y0_0_0 theta v_0_0 dW0_0_0 dW1_0_0 := by
  simp only [Gen.grad_milstein_i_scalar_11_gf_gy_0_0, Gen.grad_milstein_i_scalar_11_gf_ty_0_0]
  generalize Gen.grad_milstein_i_scalar_11_gf_f_d1_0d13626a177a sqrt f f_d1 f_d2 g g_d1 g_d2 t0 t2 dt y0_0_0 theta v_0_0 dW0_0_0 dW1_0_0 = a0
  generalize Gen.grad_milstein_i_scalar_11_gf_f_d1_b39c2b677c13 sqrt f f_d1 f_d2 g g_d1 g_d2 t0 t2 dt y0_0_0 theta v_0_0 dW0_0_0 dW1_0_0 = a1
  generalize Gen.grad_milstein_i_scalar_11_gf_g_d1_02b813f80bf9 sqrt f f_d1 f_d2 g g_d1 g_d2 t0 t2 dt y0_0_0 theta v_0_0 dW0_0_0 dW1_0_0 = a2
  generalize Gen.grad_milstein_i_scalar_11_gf_g_d1_ddd0c5e556e2 sqrt f f_d1 f_d2 g g_d1 g_d2 t0 t2 dt y0_0_0 theta v_0_0 dW0_0_0 dW1_0_0 = a3
  generalize Gen.grad_milstein_i_scalar_11_gf_g_d1_fcbd887f1bc8 sqrt f f_d1 f_d2 g g_d1 g_d2 t0 t2 dt y0_0_0 theta v_0_0 dW0_0_0 dW1_0_0 = a4
  generalize Gen.grad_milstein_i_scalar_11_gf_g_d1_fe90e523b752 sqrt f f_d1 f_d2 g g_d1 g_d2 t0 t2 dt y0_0_0 theta v_0_0 dW0_0_0 dW1_0_0 = a5
  ring

set_option maxHeartbeats 4000000 in
/-- `grad_milstein_s_scalar_11`: backprop `gth` = forward derivative `tth` -/
theorem grad_milstein_s_scalar_11_gth  (f : K → K → K → K) (f_d1 : K → K → K → K) (f_d2 : K → K → K → K) (g : K → K → K → K) (g_d1 : K → K → K → K) (g_d11 : K → K → K → K) (g_d12 : K → K → K → K) (g_d2 : K → K → K → K) (t0 t2 dt y0_0_0 theta v_0_0 dW0_0_0 dW1_0_0 : K) :
    Gen.grad_milstein_s_scalar_11_gth f f_d1 f_d2 g g_d1 g_d11 g_d12 g_d2 t0 t2 dt y0_0_0 theta v_0_0 dW0_0_0 dW1_0_0 = Gen.grad_milstein_s_scalar_11_tth f f_d1 f_d2 g g_d1 g_d11 g_d12 g_d2 t0 t2 dt y0_0_0 theta v_0_0 dW0_0_0 dW1_0_0 := by
  simp only [Gen.grad_milstein_s_scalar_11_gth, Gen.grad_milstein_s_scalar_11_tth]
  generalize Gen.grad_milstein_s_scalar_11_f_d1_d1594caba5a3 f f_d1 f_d2 g g_d1 g_d11 g_d12 g_d2 t0 t2 dt y0_0_0 theta v_0_0 dW0_0_0 dW1_0_0 = a0
  generalize Gen.grad_milstein_s_scalar_11_f_d2_19f2c5491e7e f f_d1 f_d2 g g_d1 g_d11 g_d12 g_d2 t0 t2 dt y0_0_0 theta v_0_0 dW0_0_0 dW1_0_0 = a1
  generalize Gen.grad_milstein_s_scalar_11_f_d2_75ad011491cf f f_d1 f_d2 g g_d1 g_d11 g_d12 g_d2 t0 t2 dt y0_0_0 theta v_0_0 dW0_0_0 dW1_0_0 = a2
  generalize Gen.grad_milstein_s_scalar_11_g_91660bdd818e f f_d1 f_d2 g g_d1 g_d11 g_d12 g_d2 t0 t2 dt y0_0_0 theta v_0_0 dW0_0_0 dW1_0_0 = a3
  generalize Gen.grad_milstein_s_scalar_11_g_d11_ac6c316b1b1e f f_d1 f_d2 g g_d1 g_d11 g_d12 g_d2 t0 t2 dt y0_0_0 theta v_0_0 dW0_0_0 dW1_0_0 = a4
  generalize Gen.grad_milstein_s_scalar_11_g_d12_40f4a140374f f f_d1 f_d2 g g_d1 g_d11 g_d12 g_d2 t0 t2 dt y0_0_0 theta v_0_0 dW0_0_0 dW1_0_0 = a5
  generalize Gen.grad_milstein_s_scalar_11_g_d12_a9aa2e37d5f4 f f_d1 f_d2 g g_d1 g_d11 g_d12 g_d2 t0 t2 dt y0_0_0 theta v_0_0 dW0_0_0 dW1_0_0 = a6
  generalize Gen.grad_milstein_s_scalar_11_g_d1_1704cf843a85 f f_d1 f_d2 g g_d1 g_d11 g_d12 g_d2 t0 t2 dt y0_0_0 theta v_0_0 dW0_0_0 dW1_0_0 = a7
  generalize Gen.grad_milstein_s_scalar_11_g_d1_ddd0c5e556e2 f f_d1 f_d2 g g_d1 g_d11 g_d12 g_d2 t0 t2 dt y0_0_0 theta v_0_0 dW0_0_0 dW1_0_0 = a8
  generalize Gen.grad_milstein_s_scalar_11_g_d2_722b7a6bbfae f f_d1 f_d2 g g_d1 g_d11 g_d12 g_d2 t0 t2 dt y0_0_0 theta v_0_0 dW0_0_0 dW1_0_0 = a9
  generalize Gen.grad_milstein_s_scalar_11_g_d2_b13a46e3cda9 f f_d1 f_d2 g g_d1 g_d11 g_d12 g_d2 t0 t2 dt y0_0_0 theta v_0_0 dW0_0_0 dW1_0_0 = a10
  generalize Gen.grad_milstein_s_scalar_11_g_db15086d257d f f_d1 f_d2 g g_d1 g_d11 g_d12 g_d2 t0 t2 dt y0_0_0 theta v_0_0 dW0_0_0 dW1_0_0 = a11
  ring

set_option maxHeartbeats 4000000 in
/-- `grad_milstein_s_scalar_11`: backprop `gy_0_0` = forward derivative `ty_0_0` -/
theorem grad_milstein_s_scalar_11_gy_0_0  (f : K → K → K → K) (f_d1 : K → K → K → K) (f_d2 : K → K → K → K) (g : K → K → K → K) (g_d1 : K → K → K → K) (g_d11 : K → K → K → K) (g_d12 : K → K → K → K) (g_d2 : K → K → K → K) (t0 t2 dt y0_0_0 theta v_0_0 dW0_0_0 dW1_0_0 : K) :
    Gen.grad_milstein_s_scalar_11_gy_0_0 f f_d1 f_d2 g g_d1 g_d11 g_d12 g_d2 t0 t2 dt y0_0_0 theta v_0_0 dW0_0_0 dW1_0_0 = Gen.grad_milstein_s_scalar_11_ty_0_0 f f_d1 f_d2 g g_d1 g_d11 g_d12 g_d2 t0 t2 dt y0_0_0 theta v_0_0 dW0_0_0 dW1_0_0 := by
  simp only [Gen.grad_milstein_s_scalar_11_gy_0_0, Gen.grad_milstein_s_scalar_11_ty_0_0]
  generalize Gen.grad_milstein_s_scalar_11_f_d1_b39c2b677c13 f f_d1 f_d2 g g_d1 g_d11 g_d12 g_d2 t0 t2 dt y0_0_0 theta v_0_0 dW0_0_0 dW1_0_0 = a0
  generalize Gen.grad_milstein_s_scalar_11_f_d1_d1594caba5a3 f f_d1 f_d2 g g_d1 g_d11 g_d12 g_d2 t0 t2 dt y0_0_0 theta v_0_0 dW0_0_0 dW1_0_0 = a1
  generalize Gen.grad_milstein_s_scalar_11_g_91660bdd818e f f_d1 f_d2 g g_d1 g_d11 g_d12 g_d2 t0 t2 dt y0_0_0 theta v_0_0 dW0_0_0 dW1_0_0 = a2
  generalize Gen.grad_milstein_s_scalar_11_g_d11_9d3773187952 f f_d1 f_d2 g g_d1 g_d11 g_d12 g_d2 t0 t2 dt y0_0_0 theta v_0_0 dW0_0_0 dW1_0_0 = a3
  generalize Gen.grad_milstein_s_scalar_11_g_d11_ac6c316b1b1e f f_d1 f_d2 g g_d1 g_d11 g_d12 g_d2 t0 t2 dt y0_0_0 theta v_0_0 dW0_0_0 dW1_0_0 = a4
  generalize Gen.grad_milstein_s_scalar_11_g_d1_1704cf843a85 f f_d1 f_d2 g g_d1 g_d11 g_d12 g_d2 t0 t2 dt y0_0_0 theta v_0_0 dW0_0_0 dW1_0_0 = a5
  generalize Gen.grad_milstein_s_scalar_11_g_d1_ddd0c5e556e2 f f_d1 f_d2 g g_d1 g_d11 g_d12 g_d2 t0 t2 dt y0_0_0 theta v_0_0 dW0_0_0 dW1_0_0 = a6
  generalize Gen.grad_milstein_s_scalar_11_g_db15086d257d f f_d1 f_d2 g g_d1 g_d11 g_d12 g_d2 t0 t2 dt y0_0_0 theta v_0_0 dW0_0_0 dW1_0_0 = a7
  ring

set_option maxHeartbeats 4000000 in
/-- `gradp_srk_i_additive_11`: backprop `gth` = forward derivative `tth` -/
theorem gradp_srk_i_additive_11_gth  (f : K → K → K → K) (f_d1 : K → K → K → K) (f_d2 : K → K → K → K) (g : K → K → K) (g_d1 : K → K → K) (t0 t2 dt y0_0_0 theta v_0_0 dW0_0_0 dW1_0_0 U0_0_0 U1_0_0 : K) :
    Gen.gradp_srk_i_additive_11_gth f f_d1 f_d2 g g_d1 t0 t2 dt y0_0_0 theta v_0_0 dW0_0_0 dW1_0_0 U0_0_0 U1_0_0 = Gen.gradp_srk_i_additive_11_tth f f_d1 f_d2 g g_d1 t0 t2 dt y0_0_0 theta v_0_0 dW0_0_0 dW1_0_0 U0_0_0 U1_0_0 := by
  simp only [Gen.gradp_srk_i_additive_11_gth, Gen.gradp_srk_i_additive_11_tth]
  generalize Gen.gradp_srk_i_additive_11_f_d1_545967cf36f9 f f_d1 f_d2 g g_d1 t0 t2 dt y0_0_0 theta v_0_0 dW0_0_0 dW1_0_0 U0_0_0 U1_0_0 = a0
  generalize Gen.gradp_srk_i_additive_11_f_d1_64d33f84f551 f f_d1 f_d2 g g_d1 t0 t2 dt y0_0_0 theta v_0_0 dW0_0_0 dW1_0_0 U0_0_0 U1_0_0 = a1
  generalize Gen.gradp_srk_i_additive_11_f_d1_9b8e7a820dfa f f_d1 f_d2 g g_d1 t0 t2 dt y0_0_0 theta v_0_0 dW0_0_0 dW1_0_0 U0_0_0 U1_0_0 = a2
  generalize Gen.gradp_srk_i_additive_11_f_d2_30982717492d f f_d1 f_d2 g g_d1 t0 t2 dt y0_0_0 theta v_0_0 dW0_0_0 dW1_0_0 U0_0_0 U1_0_0 = a3
  generalize Gen.gradp_srk_i_additive_11_f_d2_310d86aaeece f f_d1 f_d2 g g_d1 t0 t2 dt y0_0_0 theta v_0_0 dW0_0_0 dW1_0_0 U0_0_0 U1_0_0 = a4
  generalize Gen.gradp_srk_i_additive_11_f_d2_a07465717661 f f_d1 f_d2 g g_d1 t0 t2 dt y0_0_0 theta v_0_0 dW0_0_0 dW1_0_0 U0_0_0 U1_0_0 = a5
  generalize Gen.gradp_srk_i_additive_11_f_d2_ed095023b578 f f_d1 f_d2 g g_d1 t0 t2 dt y0_0_0 theta v_0_0 dW0_0_0 dW1_0_0 U0_0_0 U1_0_0 = a6
  generalize Gen.gradp_srk_i_additive_11_g_d1_844941673c3d f f_d1 f_d2 g g_d1 t0 t2 dt y0_0_0 theta v_0_0 dW0_0_0 dW1_0_0 U0_0_0 U1_0_0 = a7
  generalize Gen.gradp_srk_i_additive_11_g_d1_8e9c9cac2da9 f f_d1 f_d2 g g_d1 t0 t2 dt y0_0_0 theta v_0_0 dW0_0_0 dW1_0_0 U0_0_0 U1_0_0 = a8
  generalize Gen.gradp_srk_i_additive_11_g_d1_d2534fdecd73 f f_d1 f_d2 g g_d1 t0 t2 dt y0_0_0 theta v_0_0 dW0_0_0 dW1_0_0 U0_0_0 U1_0_0 = a9
  generalize Gen.gradp_srk_i_additive_11_g_d1_dcd6717989e1 f f_d1 f_d2 g g_d1 t0 t2 dt y0_0_0 theta v_0_0 dW0_0_0 dW1_0_0 U0_0_0 U1_0_0 = a10
  ring

set_option maxHeartbeats 4000000 in
/-- `gradp_euler_heun_s_additive_11`: backprop `gth` = forward derivative `tth` -/
theorem gradp_euler_heun_s_additive_11_gth  (f : K → K → K → K) (f_d1 : K → K → K → K) (f_d2 : K → K → K → K) (g : K → K → K) (g_d1 : K → K → K) (t0 t2 dt y0_0_0 theta v_0_0 dW0_0_0 dW1_0_0 : K) :
    Gen.gradp_euler_heun_s_additive_11_gth f f_d1 f_d2 g g_d1 t0 t2 dt y0_0_0 theta v_0_0 dW0_0_0 dW1_0_0 = Gen.gradp_euler_heun_s_additive_11_tth f f_d1 f_d2 g g_d1 t0 t2 dt y0_0_0 theta v_0_0 dW0_0_0 dW1_0_0 := by
  simp only [Gen.gradp_euler_heun_s_additive_11_gth, Gen.gradp_euler_heun_s_additive_11_tth]
  generalize Gen.gradp_euler_heun_s_additive_11_f_d1_2a025112a416 f f_d1 f_d2 g g_d1 t0 t2 dt y0_0_0 theta v_0_0 dW0_0_0 dW1_0_0 = a0
  generalize Gen.gradp_euler_heun_s_additive_11_f_d2_75ad011491cf f f_d1 f_d2 g g_d1 t0 t2 dt y0_0_0 theta v_0_0 dW0_0_0 dW1_0_0 = a1
  generalize Gen.gradp_euler_heun_s_additive_11_f_d2_76acf2c8bf43 f f_d1 f_d2 g g_d1 t0 t2 dt y0_0_0 theta v_0_0 dW0_0_0 dW1_0_0 = a2
  generalize Gen.gradp_euler_heun_s_additive_11_g_d1_098edafcd8e5 f f_d1 f_d2 g g_d1 t0 t2 dt y0_0_0 theta v_0_0 dW0_0_0 dW1_0_0 = a3
  generalize Gen.gradp_euler_heun_s_additive_11_g_d1_39aaf857762f f f_d1 f_d2 g g_d1 t0 t2 dt y0_0_0 theta v_0_0 dW0_0_0 dW1_0_0 = a4
  generalize Gen.gradp_euler_heun_s_additive_11_g_d1_3d49352567ba f f_d1 f_d2 g g_d1 t0 t2 dt y0_0_0 theta v_0_0 dW0_0_0 dW1_0_0 = a5
  ring

set_option maxHeartbeats 4000000 in
/-- `gradp_heun_s_diagonal_11`: backprop `gth` = forward derivative `tth` -/
theorem gradp_heun_s_diagonal_11_gth  (f : K → K → K → K) (f_d1 : K → K → K → K) (f_d2 : K → K → K → K) (g : K → K → K → K) (g_d1 : K → K → K → K) (g_d2 : K → K → K → K) (t0 t2 dt y0_0_0 theta v_0_0 dW0_0_0 dW1_0_0 : K) :
    Gen.gradp_heun_s_diagonal_11_gth f f_d1 f_d2 g g_d1 g_d2 t0 t2 dt y0_0_0 theta v_0_0 dW0_0_0 dW1_0_0 = Gen.gradp_heun_s_diagonal_11_tth f f_d1 f_d2 g g_d1 g_d2 t0 t2 dt y0_0_0 theta v_0_0 dW0_0_0 dW1_0_0 := by
  simp only [Gen.gradp_heun_s_diagonal_11_gth, Gen.gradp_heun_s_diagonal_11_tth]
  generalize Gen.gradp_heun_s_diagonal_11_f_d1_850996a283cd f f_d1 f_d2 g g_d1 g_d2 t0 t2 dt y0_0_0 theta v_0_0 dW0_0_0 dW1_0_0 = a0
  generalize Gen.gradp_heun_s_diagonal_11_f_d1_a0c409c02ee2 f f_d1 f_d2 g g_d1 g_d2 t0 t2 dt y0_0_0 theta v_0_0 dW0_0_0 dW1_0_0 = a1
  generalize Gen.gradp_heun_s_diagonal_11_f_d1_aa6f717505bc f f_d1 f_d2 g g_d1 g_d2 t0 t2 dt y0_0_0 theta v_0_0 dW0_0_0 dW1_0_0 = a2
  generalize Gen.gradp_heun_s_diagonal_11_f_d2_75ad011491cf f f_d1 f_d2 g g_d1 g_d2 t0 t2 dt y0_0_0 theta v_0_0 dW0_0_0 dW1_0_0 = a3
  generalize Gen.gradp_heun_s_diagonal_11_f_d2_85fb27cb9ecd f f_d1 f_d2 g g_d1 g_d2 t0 t2 dt y0_0_0 theta v_0_0 dW0_0_0 dW1_0_0 = a4
  generalize Gen.gradp_heun_s_diagonal_11_f_d2_f0ddd094ca46 f f_d1 f_d2 g g_d1 g_d2 t0 t2 dt y0_0_0 theta v_0_0 dW0_0_0 dW1_0_0 = a5
  generalize Gen.gradp_heun_s_diagonal_11_f_d2_f2b7d9350614 f f_d1 f_d2 g g_d1 g_d2 t0 t2 dt y0_0_0 theta v_0_0 dW0_0_0 dW1_0_0 = a6
  generalize Gen.gradp_heun_s_diagonal_11_g_d1_32d16569e2d0 f f_d1 f_d2 g g_d1 g_d2 t0 t2 dt y0_0_0 theta v_0_0 dW0_0_0 dW1_0_0 = a7
  generalize Gen.gradp_heun_s_diagonal_11_g_d1_506c676fd130 f f_d1 f_d2 g g_d1 g_d2 t0 t2 dt y0_0_0 theta v_0_0 dW0_0_0 dW1_0_0 = a8
  generalize Gen.gradp_heun_s_diagonal_11_g_d1_6a8c15d1c454 f f_d1 f_d2 g g_d1 g_d2 t0 t2 dt y0_0_0 theta v_0_0 dW0_0_0 dW1_0_0 = a9
  generalize Gen.gradp_heun_s_diagonal_11_g_d2_02f255630af5 f f_d1 f_d2 g g_d1 g_d2 t0 t2 dt y0_0_0 theta v_0_0 dW0_0_0 dW1_0_0 = a10
  generalize Gen.gradp_heun_s_diagonal_11_g_d2_4079b3c76e81 f f_d1 f_d2 g g_d1 g_d2 t0 t2 dt y0_0_0 theta v_0_0 dW0_0_0 dW1_0_0 = a11
  generalize Gen.gradp_heun_s_diagonal_11_g_d2_46fb04d4bfcb f f_d1 f_d2 g g_d1 g_d2 t0 t2 dt y0_0_0 theta v_0_0 dW0_0_0 dW1_0_0 = a12
  generalize Gen.gradp_heun_s_diagonal_11_g_d2_722b7a6bbfae f f_d1 f_d2 g g_d1 g_d2 t0 t2 dt y0_0_0 theta v_0_0 dW0_0_0 dW1_0_0 = a13
  ring

set_option maxHeartbeats 4000000 in
/-- `gradp_heun_s_general_11`: backprop `gth` = forward derivative `tth` -/
theorem gradp_heun_s_general_11_gth  (f : K → K → K → K) (f_d1 : K → K → K → K) (f_d2 : K → K → K → K) (g : K → K → K → K) (g_d1 : K → K → K → K) (g_d2 : K → K → K → K) (t0 t2 dt y0_0_0 theta v_0_0 dW0_0_0 dW1_0_0 : K) :
    Gen.gradp_heun_s_general_11_gth f f_d1 f_d2 g g_d1 g_d2 t0 t2 dt y0_0_0 theta v_0_0 dW0_0_0 dW1_0_0 = Gen.gradp_heun_s_general_11_tth f f_d1 f_d2 g g_d1 g_d2 t0 t2 dt y0_0_0 theta v_0_0 dW0_0_0 dW1_0_0 := by
  simp only [Gen.gradp_heun_s_general_11_gth, Gen.gradp_heun_s_general_11_tth]
  generalize Gen.gradp_heun_s_general_11_f_d1_850996a283cd f f_d1 f_d2 g g_d1 g_d2 t0 t2 dt y0_0_0 theta v_0_0 dW0_0_0 dW1_0_0 = a0
  generalize Gen.gradp_heun_s_general_11_f_d1_a0c409c02ee2 f f_d1 f_d2 g g_d1 g_d2 t0 t2 dt y0_0_0 theta v_0_0 dW0_0_0 dW1_0_0 = a1
  generalize Gen.gradp_heun_s_general_11_f_d1_aa6f717505bc f f_d1 f_d2 g g_d1 g_d2 t0 t2 dt y0_0_0 theta v_0_0 dW0_0_0 dW1_0_0 = a2
  generalize Gen.gradp_heun_s_general_11_f_d2_75ad011491cf f f_d1 f_d2 g g_d1 g_d2 t0 t2 dt y0_0_0 theta v_0_0 dW0_0_0 dW1_0_0 = a3
  generalize Gen.gradp_heun_s_general_11_f_d2_85fb27cb9ecd f f_d1 f_d2 g g_d1 g_d2 t0 t2 dt y0_0_0 theta v_0_0 dW0_0_0 dW1_0_0 = a4
  generalize Gen.gradp_heun_s_general_11_f_d2_f0ddd094ca46 f f_d1 f_d2 g g_d1 g_d2 t0 t2 dt y0_0_0 theta v_0_0 dW0_0_0 dW1_0_0 = a5
  generalize Gen.gradp_heun_s_general_11_f_d2_f2b7d9350614 f f_d1 f_d2 g g_d1 g_d2 t0 t2 dt y0_0_0 theta v_0_0 dW0_0_0 dW1_0_0 = a6
  generalize Gen.gradp_heun_s_general_11_g_d1_32d16569e2d0 f f_d1 f_d2 g g_d1 g_d2 t0 t2 dt y0_0_0 theta v_0_0 dW0_0_0 dW1_0_0 = a7
  generalize Gen.gradp_heun_s_general_11_g_d1_506c676fd130 f f_d1 f_d2 g g_d1 g_d2 t0 t2 dt y0_0_0 theta v_0_0 dW0_0_0 dW1_0_0 = a8
  generalize Gen.gradp_heun_s_general_11_g_d1_6a8c15d1c454 f f_d1 f_d2 g g_d1 g_d2 t0 t2 dt y0_0_0 theta v_0_0 dW0_0_0 dW1_0_0 = a9
  generalize Gen.gradp_heun_s_general_11_g_d2_02f255630af5 f f_d1 f_d2 g g_d1 g_d2 t0 t2 dt y0_0_0 theta v_0_0 dW0_0_0 dW1_0_0 = a10
  generalize Gen.gradp_heun_s_general_11_g_d2_4079b3c76e81 f f_d1 f_d2 g g_d1 g_d2 t0 t2 dt y0_0_0 theta v_0_0 dW0_0_0 dW1_0_0 = a11
  generalize Gen.gradp_heun_s_general_11_g_d2_46fb04d4bfcb f f_d1 f_d2 g g_d1 g_d2 t0 t2 dt y0_0_0 theta v_0_0 dW0_0_0 dW1_0_0 = a12
  generalize Gen.gradp_heun_s_general_11_g_d2_722b7a6bbfae f f_d1 f_d2 g g_d1 g_d2 t0 t2 dt y0_0_0 theta v_0_0 dW0_0_0 dW1_0_0 = a13
  ring

set_option maxHeartbeats 4000000 in
/-- `gradp_midpoint_s_scalar_11`: backprop `gth` = forward derivative `tth` -/
theorem gradp_midpoint_s_scalar_11_gth  (f : K → K → K → K) (f_d1 : K → K → K → K) (f_d2 : K → K → K → K) (g : K → K → K → K) (g_d1 : K → K → K → K) (g_d2 : K → K → K → K) (t0 t2 dt y0_0_0 theta v_0_0 dW0_0_0 dW1_0_0 : K) :
    Gen.gradp_midpoint_s_scalar_11_gth f f_d1 f_d2 g g_d1 g_d2 t0 t2 dt y0_0_0 theta v_0_0 dW0_0_0 dW1_0_0 = Gen.gradp_midpoint_s_scalar_11_tth f f_d1 f_d2 g g_d1 g_d2 t0 t2 dt y0_0_0 theta v_0_0 dW0_0_0 dW1_0_0 := by
  simp only [Gen.gradp_midpoint_s_scalar_11_gth, Gen.gradp_midpoint_s_scalar_11_tth]
  generalize Gen.gradp_midpoint_s_scalar_11_f_d1_5ee6dd087015 f f_d1 f_d2 g g_d1 g_d2 t0 t2 dt y0_0_0 theta v_0_0 dW0_0_0 dW1_0_0 = a0
  generalize Gen.gradp_midpoint_s_scalar_11_f_d1_703972b470e0 f f_d1 f_d2 g g_d1 g_d2 t0 t2 dt y0_0_0 theta v_0_0 dW0_0_0 dW1_0_0 = a1
  generalize Gen.gradp_midpoint_s_scalar_11_f_d1_ea194427e5d2 f f_d1 f_d2 g g_d1 g_d2 t0 t2 dt y0_0_0 theta v_0_0 dW0_0_0 dW1_0_0 = a2
  generalize Gen.gradp_midpoint_s_scalar_11_f_d2_0b924ab0a277 f f_d1 f_d2 g g_d1 g_d2 t0 t2 dt y0_0_0 theta v_0_0 dW0_0_0 dW1_0_0 = a3
  generalize Gen.gradp_midpoint_s_scalar_11_f_d2_75ad011491cf f f_d1 f_d2 g g_d1 g_d2 t0 t2 dt y0_0_0 theta v_0_0 dW0_0_0 dW1_0_0 = a4
  generalize Gen.gradp_midpoint_s_scalar_11_f_d2_7af3983cc4c0 f f_d1 f_d2 g g_d1 g_d2 t0 t2 dt y0_0_0 theta v_0_0 dW0_0_0 dW1_0_0 = a5
  generalize Gen.gradp_midpoint_s_scalar_11_f_d2_d7cbc9408b90 f f_d1 f_d2 g g_d1 g_d2 t0 t2 dt y0_0_0 theta v_0_0 dW0_0_0 dW1_0_0 = a6
  generalize Gen.gradp_midpoint_s_scalar_11_g_d1_4cebf89ea8f9 f f_d1 f_d2 g g_d1 g_d2 t0 t2 dt y0_0_0 theta v_0_0 dW0_0_0 dW1_0_0 = a7
  generalize Gen.gradp_midpoint_s_scalar_11_g_d1_6efd91c6bd6e f f_d1 f_d2 g g_d1 g_d2 t0 t2 dt y0_0_0 theta v_0_0 dW0_0_0 dW1_0_0 = a8
  generalize Gen.gradp_midpoint_s_scalar_11_g_d1_76b5237ed2e6 f f_d1 f_d2 g g_d1 g_d2 t0 t2 dt y0_0_0 theta v_0_0 dW0_0_0 dW1_0_0 = a9
  generalize Gen.gradp_midpoint_s_scalar_11_g_d2_722b7a6bbfae f f_d1 f_d2 g g_d1 g_d2 t0 t2 dt y0_0_0 theta v_0_0 dW0_0_0 dW1_0_0 = a10
  generalize Gen.gradp_midpoint_s_scalar_11_g_d2_971f06219250 f f_d1 f_d2 g g_d1 g_d2 t0 t2 dt y0_0_0 theta v_0_0 dW0_0_0 dW1_0_0 = a11
  generalize Gen.gradp_midpoint_s_scalar_11_g_d2_e3437f9b71a5 f f_d1 f_d2 g g_d1 g_d2 t0 t2 dt y0_0_0 theta v_0_0 dW0_0_0 dW1_0_0 = a12
  generalize Gen.gradp_midpoint_s_scalar_11_g_d2_ee9a050cb9fa f f_d1 f_d2 g g_d1 g_d2 t0 t2 dt y0_0_0 theta v_0_0 dW0_0_0 dW1_0_0 = a13
  ring

set_option maxHeartbeats 4000000 in
/-- `gradp_log_ode_s_additive_11`: backprop `gth` = forward derivative `tth` -/
theorem gradp_log_ode_s_additive_11_gth  (f : K → K → K → K) (f_d1 : K → K → K → K) (f_d2 : K → K → K → K) (g : K → K → K) (g_d1 : K → K → K) (t0 t2 dt y0_0_0 theta v_0_0 dW0_0_0 dW1_0_0 U0_0_0 U1_0_0 A0_0_0_0 A1_0_0_0 : K) :
    Gen.gradp_log_ode_s_additive_11_gth f f_d1 f_d2 g g_d1 t0 t2 dt y0_0_0 theta v_0_0 dW0_0_0 dW1_0_0 U0_0_0 U1_0_0 A0_0_0_0 A1_0_0_0 = Gen.gradp_log_ode_s_additive_11_tth f f_d1 f_d2 g g_d1 t0 t2 dt y0_0_0 theta v_0_0 dW0_0_0 dW1_0_0 U0_0_0 U1_0_0 A0_0_0_0 A1_0_0_0 := by
  simp only [Gen.gradp_log_ode_s_additive_11_gth, Gen.gradp_log_ode_s_additive_11_tth]
  generalize Gen.gradp_log_ode_s_additive_11_f_d1_0d0c9a3077c6 f f_d1 f_d2 g g_d1 t0 t2 dt y0_0_0 theta v_0_0 dW0_0_0 dW1_0_0 U0_0_0 U1_0_0 A0_0_0_0 A1_0_0_0 = a0
  generalize Gen.gradp_log_ode_s_additive_11_f_d1_e98ae284e0cb f f_d1 f_d2 g g_d1 t0 t2 dt y0_0_0 theta v_0_0 dW0_0_0 dW1_0_0 U0_0_0 U1_0_0 A0_0_0_0 A1_0_0_0 = a1
  generalize Gen.gradp_log_ode_s_additive_11_f_d1_ff7f21209d68 f f_d1 f_d2 g g_d1 t0 t2 dt y0_0_0 theta v_0_0 dW0_0_0 dW1_0_0 U0_0_0 U1_0_0 A0_0_0_0 A1_0_0_0 = a2
  generalize Gen.gradp_log_ode_s_additive_11_f_d2_29b33e7b64ab f f_d1 f_d2 g g_d1 t0 t2 dt y0_0_0 theta v_0_0 dW0_0_0 dW1_0_0 U0_0_0 U1_0_0 A0_0_0_0 A1_0_0_0 = a3
  generalize Gen.gradp_log_ode_s_additive_11_f_d2_75ad011491cf f f_d1 f_d2 g g_d1 t0 t2 dt y0_0_0 theta v_0_0 dW0_0_0 dW1_0_0 U0_0_0 U1_0_0 A0_0_0_0 A1_0_0_0 = a4
  generalize Gen.gradp_log_ode_s_additive_11_f_d2_9c26a268e4ad f f_d1 f_d2 g g_d1 t0 t2 dt y0_0_0 theta v_0_0 dW0_0_0 dW1_0_0 U0_0_0 U1_0_0 A0_0_0_0 A1_0_0_0 = a5
  generalize Gen.gradp_log_ode_s_additive_11_f_d2_d17937baee3f f f_d1 f_d2 g g_d1 t0 t2 dt y0_0_0 theta v_0_0 dW0_0_0 dW1_0_0 U0_0_0 U1_0_0 A0_0_0_0 A1_0_0_0 = a6
  generalize Gen.gradp_log_ode_s_additive_11_g_d1_39aaf857762f f f_d1 f_d2 g g_d1 t0 t2 dt y0_0_0 theta v_0_0 dW0_0_0 dW1_0_0 U0_0_0 U1_0_0 A0_0_0_0 A1_0_0_0 = a7
  generalize Gen.gradp_log_ode_s_additive_11_g_d1_3d49352567ba f f_d1 f_d2 g g_d1 t0 t2 dt y0_0_0 theta v_0_0 dW0_0_0 dW1_0_0 U0_0_0 U1_0_0 A0_0_0_0 A1_0_0_0 = a8
  generalize Gen.gradp_log_ode_s_additive_11_g_d1_d6c79566b23d f f_d1 f_d2 g g_d1 t0 t2 dt y0_0_0 theta v_0_0 dW0_0_0 dW1_0_0 U0_0_0 U1_0_0 A0_0_0_0 A1_0_0_0 = a9
  generalize Gen.gradp_log_ode_s_additive_11_g_d1_e503fc41dafc f f_d1 f_d2 g g_d1 t0 t2 dt y0_0_0 theta v_0_0 dW0_0_0 dW1_0_0 U0_0_0 U1_0_0 A0_0_0_0 A1_0_0_0 = a10
  ring

set_option maxHeartbeats 4000000 in
/-- `gradp_reversible_heun_s_diagonal_11`: backprop `gth` = forward derivative `tth` -/
theorem gradp_reversible_heun_s_diagonal_11_gth  (f : K → K → K → K) (f_d1 : K → K → K → K) (f_d2 : K → K → K → K) (g : K → K → K → K) (g_d1 : K → K → K → K) (g_d2 : K → K → K → K) (t0 t2 dt y0_0_0 theta v_0_0 dW0_0_0 dW1_0_0 : K) :
    Gen.gradp_reversible_heun_s_diagonal_11_gth f f_d1 f_d2 g g_d1 g_d2 t0 t2 dt y0_0_0 theta v_0_0 dW0_0_0 dW1_0_0 = Gen.gradp_reversible_heun_s_diagonal_11_tth f f_d1 f_d2 g g_d1 g_d2 t0 t2 dt y0_0_0 theta v_0_0 dW0_0_0 dW1_0_0 := by
  simp only [Gen.gradp_reversible_heun_s_diagonal_11_gth, Gen.gradp_reversible_heun_s_diagonal_11_tth]
  generalize Gen.gradp_reversible_heun_s_diagonal_11_f_d1_668ff2e067df f f_d1 f_d2 g g_d1 g_d2 t0 t2 dt y0_0_0 theta v_0_0 dW0_0_0 dW1_0_0 = a0
  generalize Gen.gradp_reversible_heun_s_diagonal_11_f_d1_7d8b6bbb9a6e f f_d1 f_d2 g g_d1 g_d2 t0 t2 dt y0_0_0 theta v_0_0 dW0_0_0 dW1_0_0 = a1
  generalize Gen.gradp_reversible_heun_s_diagonal_11_f_d2_75ad011491cf f f_d1 f_d2 g g_d1 g_d2 t0 t2 dt y0_0_0 theta v_0_0 dW0_0_0 dW1_0_0 = a2
  generalize Gen.gradp_reversible_heun_s_diagonal_11_f_d2_aa59138e4563 f f_d1 f_d2 g g_d1 g_d2 t0 t2 dt y0_0_0 theta v_0_0 dW0_0_0 dW1_0_0 = a3
  generalize Gen.gradp_reversible_heun_s_diagonal_11_f_d2_f85d5dcbccb1 f f_d1 f_d2 g g_d1 g_d2 t0 t2 dt y0_0_0 theta v_0_0 dW0_0_0 dW1_0_0 = a4
  generalize Gen.gradp_reversible_heun_s_diagonal_11_g_d1_09229750873c f f_d1 f_d2 g g_d1 g_d2 t0 t2 dt y0_0_0 theta v_0_0 dW0_0_0 dW1_0_0 = a5
  generalize Gen.gradp_reversible_heun_s_diagonal_11_g_d1_18d452194dca f f_d1 f_d2 g g_d1 g_d2 t0 t2 dt y0_0_0 theta v_0_0 dW0_0_0 dW1_0_0 = a6
  generalize Gen.gradp_reversible_heun_s_diagonal_11_g_d2_722b7a6bbfae f f_d1 f_d2 g g_d1 g_d2 t0 t2 dt y0_0_0 theta v_0_0 dW0_0_0 dW1_0_0 = a7
  generalize Gen.gradp_reversible_heun_s_diagonal_11_g_d2_72ad817e521d f f_d1 f_d2 g g_d1 g_d2 t0 t2 dt y0_0_0 theta v_0_0 dW0_0_0 dW1_0_0 = a8
  generalize Gen.gradp_reversible_heun_s_diagonal_11_g_d2_b5ffc99eee28 f f_d1 f_d2 g g_d1 g_d2 t0 t2 dt y0_0_0 theta v_0_0 dW0_0_0 dW1_0_0 = a9
  ring

set_option maxHeartbeats 4000000 in
/-- `gradp_reversible_heun_s_general_11`: backprop `gth` = forward derivative `tth` -/
theorem gradp_reversible_heun_s_general_11_gth  (f : K → K → K → K) (f_d1 : K → K → K → K) (f_d2 : K → K → K → K) (g : K → K → K → K) (g_d1 : K → K → K → K) (g_d2 : K → K → K → K) (t0 t2 dt y0_0_0 theta v_0_0 dW0_0_0 dW1_0_0 : K) :
    Gen.gradp_reversible_heun_s_general_11_gth f f_d1 f_d2 g g_d1 g_d2 t0 t2 dt y0_0_0 theta v_0_0 dW0_0_0 dW1_0_0 = Gen.gradp_reversible_heun_s_general_11_tth f f_d1 f_d2 g g_d1 g_d2 t0 t2 dt y0_0_0 theta v_0_0 dW0_0_0 dW1_0_0 := by
  simp only [Gen.gradp_reversible_heun_s_general_11_gth, Gen.gradp_reversible_heun_s_general_11_tth]
  generalize Gen.gradp_reversible_heun_s_general_11_f_d1_668ff2e067df f f_d1 f_d2 g g_d1 g_d2 t0 t2 dt y0_0_0 theta v_0_0 dW0_0_0 dW1_0_0 = a0
  generalize Gen.gradp_reversible_heun_s_general_11_f_d1_7d8b6bbb9a6e f f_d1 f_d2 g g_d1 g_d2 t0 t2 dt y0_0_0 theta v_0_0 dW0_0_0 dW1_0_0 = a1
  generalize Gen.gradp_reversible_heun_s_general_11_f_d2_75ad011491cf f f_d1 f_d2 g g_d1 g_d2 t0 t2 dt y0_0_0 theta v_0_0 dW0_0_0 dW1_0_0 = a2
  generalize Gen.gradp_reversible_heun_s_general_11_f_d2_aa59138e4563 f f_d1 f_d2 g g_d1 g_d2 t0 t2 dt y0_0_0 theta v_0_0 dW0_0_0 dW1_0_0 = a3
  generalize Gen.gradp_reversible_heun_s_general_11_f_d2_f85d5dcbccb1 f f_d1 f_d2 g g_d1 g_d2 t0 t2 dt y0_0_0 theta v_0_0 dW0_0_0 dW1_0_0 = a4
  generalize Gen.gradp_reversible_heun_s_general_11_g_d1_09229750873c f f_d1 f_d2 g g_d1 g_d2 t0 t2 dt y0_0_0 theta v_0_0 dW0_0_0 dW1_0_0 = a5
  generalize Gen.gradp_reversible_heun_s_general_11_g_d1_18d452194dca f f_d1 f_d2 g g_d1 g_d2 t0 t2 dt y0_0_0 theta v_0_0 dW0_0_0 dW1_0_0 = a6
  generalize Gen.gradp_reversible_heun_s_general_11_g_d2_722b7a6bbfae f f_d1 f_d2 g g_d1 g_d2 t0 t2 dt y0_0_0 theta v_0_0 dW0_0_0 dW1_0_0 = a7
  generalize Gen.gradp_reversible_heun_s_general_11_g_d2_72ad817e521d f f_d1 f_d2 g g_d1 g_d2 t0 t2 dt y0_0_0 theta v_0_0 dW0_0_0 dW1_0_0 = a8
  generalize Gen.gradp_reversible_heun_s_general_11_g_d2_b5ffc99eee28 f f_d1 f_d2 g g_d1 g_d2 t0 t2 dt y0_0_0 theta v_0_0 dW0_0_0 dW1_0_0 = a9
  ring

set_option maxHeartbeats 4000000 in
/-- `grad_srk_i_scalar_21`: backprop `gth` = forward derivative `tth` -/
theorem grad_srk_i_scalar_21_gth (sqrt : K → K) (f0 : K → K → K → K → K) (f0_d1 : K → K → K → K → K) (f0_d2 : K → K → K → K → K) (f0_d3 : K → K → K → K → K) (f1 : K → K → K → K → K) (f1_d1 : K → K → K → K → K) (f1_d2 : K → K → K → K → K) (f1_d3 : K → K → K → K → K) (g00 : K → K → K → K → K) (g00_d1 : K → K → K → K → K) (g00_d2 : K → K → K → K → K) (g00_d3 : K → K → K → K → K) (g10 : K → K → K → K → K) (g10_d1 : K → K → K → K → K) (g10_d2 : K → K → K → K → K) (g10_d3 : K → K → K → K → K) (t0 t2 dt y0_0_0 y0_0_1 theta v_0_0 v_0_1 dW0_0_0 U0_0_0 : K) :
    Gen.grad_srk_i_scalar_21_gth sqrt f0 f0_d1 f0_d2 f0_d3 f1 f1_d1 f1_d2 f1_d3 g00 g00_d1 g00_d2 g00_d3 g10 g10_d1 g10_d2 g10_d3 t0 t2 dt y0_0_0 y0_0_1 theta v_0_0 v_0_1 dW0_0_0 U0_0_0 = Gen.grad_srk_i_scalar_21_tth sqrt f0 f0_d1 f0_d2 f0_d3 f1 f1_d1 f1_d2 f1_d3 g00 g00_d1 g00_d2 g00_d3 g10 g10_d1 g10_d2 g10_d3 t0 t2 dt y0_0_0 y0_0_1 theta v_0_0 v_0_1 dW0_0_0 U0_0_0 := by
  simp only [Gen.grad_srk_i_scalar_21_gth, Gen.grad_srk_i_scalar_21_tth]
  generalize Gen.grad_srk_i_scalar_21_f0_d1_048a3ae647bb sqrt f0 f0_d1 f0_d2 f0_d3 f1 f1_d1 f1_d2 f1_d3 g00 g00_d1 g00_d2 g00_d3 g10 g10_d1 g10_d2 g10_d3 t0 t2 dt y0_0_0 y0_0_1 theta v_0_0 v_0_1 dW0_0_0 U0_0_0 = a0
  generalize Gen.grad_srk_i_scalar_21_f0_d1_0d6da03f05d2 sqrt f0 f0_d1 f0_d2 f0_d3 f1 f1_d1 f1_d2 f1_d3 g00 g00_d1 g00_d2 g00_d3 g10 g10_d1 g10_d2 g10_d3 t0 t2 dt y0_0_0 y0_0_1 theta v_0_0 v_0_1 dW0_0_0 U0_0_0 = a1
  generalize Gen.grad_srk_i_scalar_21_f0_d1_ec181339d940 sqrt f0 f0_d1 f0_d2 f0_d3 f1 f1_d1 f1_d2 f1_d3 g00 g00_d1 g00_d2 g00_d3 g10 g10_d1 g10_d2 g10_d3 t0 t2 dt y0_0_0 y0_0_1 theta v_0_0 v_0_1 dW0_0_0 U0_0_0 = a2
  generalize Gen.grad_srk_i_scalar_21_f0_d2_325fb4cfeeb2 sqrt f0 f0_d1 f0_d2 f0_d3 f1 f1_d1 f1_d2 f1_d3 g00 g00_d1 g00_d2 g00_d3 g10 g10_d1 g10_d2 g10_d3 t0 t2 dt y0_0_0 y0_0_1 theta v_0_0 v_0_1 dW0_0_0 U0_0_0 = a3
  generalize Gen.grad_srk_i_scalar_21_f0_d2_78a5f58013c7 sqrt f0 f0_d1 f0_d2 f0_d3 f1 f1_d1 f1_d2 f1_d3 g00 g00_d1 g00_d2 g00_d3 g10 g10_d1 g10_d2 g10_d3 t0 t2 dt y0_0_0 y0_0_1 theta v_0_0 v_0_1 dW0_0_0 U0_0_0 = a4
  generalize Gen.grad_srk_i_scalar_21_f0_d2_ccf1535f12fd sqrt f0 f0_d1 f0_d2 f0_d3 f1 f1_d1 f1_d2 f1_d3 g00 g00_d1 g00_d2 g00_d3 g10 g10_d1 g10_d2 g10_d3 t0 t2 dt y0_0_0 y0_0_1 theta v_0_0 v_0_1 dW0_0_0 U0_0_0 = a5
  generalize Gen.grad_srk_i_scalar_21_f0_d3_1033d7204803 sqrt f0 f0_d1 f0_d2 f0_d3 f1 f1_d1 f1_d2 f1_d3 g00 g00_d1 g00_d2 g00_d3 g10 g10_d1 g10_d2 g10_d3 t0 t2 dt y0_0_0 y0_0_1 theta v_0_0 v_0_1 dW0_0_0 U0_0_0 = a6
  generalize Gen.grad_srk_i_scalar_21_f0_d3_7056f1fba1f4 sqrt f0 f0_d1 f0_d2 f0_d3 f1 f1_d1 f1_d2 f1_d3 g00 g00_d1 g00_d2 g00_d3 g10 g10_d1 g10_d2 g10_d3 t0 t2 dt y0_0_0 y0_0_1 theta v_0_0 v_0_1 dW0_0_0 U0_0_0 = a7
  generalize Gen.grad_srk_i_scalar_21_f0_d3_99cae4af778e sqrt f0 f0_d1 f0_d2 f0_d3 f1 f1_d1 f1_d2 f1_d3 g00 g00_d1 g00_d2 g00_d3 g10 g10_d1 g10_d2 g10_d3 t0 t2 dt y0_0_0 y0_0_1 theta v_0_0 v_0_1 dW0_0_0 U0_0_0 = a8
  generalize Gen.grad_srk_i_scalar_21_f0_d3_c42a43897dac sqrt f0 f0_d1 f0_d2 f0_d3 f1 f1_d1 f1_d2 f1_d3 g00 g00_d1 g00_d2 g00_d3 g10 g10_d1 g10_d2 g10_d3 t0 t2 dt y0_0_0 y0_0_1 theta v_0_0 v_0_1 dW0_0_0 U0_0_0 = a9
  generalize Gen.grad_srk_i_scalar_21_f1_d1_11f8b33c18d7 sqrt f0 f0_d1 f0_d2 f0_d3 f1 f1_d1 f1_d2 f1_d3 g00 g00_d1 g00_d2 g00_d3 g10 g10_d1 g10_d2 g10_d3 t0 t2 dt y0_0_0 y0_0_1 theta v_0_0 v_0_1 dW0_0_0 U0_0_0 = a10
  generalize Gen.grad_srk_i_scalar_21_f1_d1_7db86f6d49e8 sqrt f0 f0_d1 f0_d2 f0_d3 f1 f1_d1 f1_d2 f1_d3 g00 g00_d1 g00_d2 g00_d3 g10 g10_d1 g10_d2 g10_d3 t0 t2 dt y0_0_0 y0_0_1 theta v_0_0 v_0_1 dW0_0_0 U0_0_0 = a11
  generalize Gen.grad_srk_i_scalar_21_f1_d1_bf7375131e55 sqrt f0 f0_d1 f0_d2 f0_d3 f1 f1_d1 f1_d2 f1_d3 g00 g00_d1 g00_d2 g00_d3 g10 g10_d1 g10_d2 g10_d3 t0 t2 dt y0_0_0 y0_0_1 theta v_0_0 v_0_1 dW0_0_0 U0_0_0 = a12
  generalize Gen.grad_srk_i_scalar_21_f1_d2_25f7e10acdf7 sqrt f0 f0_d1 f0_d2 f0_d3 f1 f1_d1 f1_d2 f1_d3 g00 g00_d1 g00_d2 g00_d3 g10 g10_d1 g10_d2 g10_d3 t0 t2 dt y0_0_0 y0_0_1 theta v_0_0 v_0_1 dW0_0_0 U0_0_0 = a13
  generalize Gen.grad_srk_i_scalar_21_f1_d2_79b001e662ef sqrt f0 f0_d1 f0_d2 f0_d3 f1 f1_d1 f1_d2 f1_d3 g00 g00_d1 g00_d2 g00_d3 g10 g10_d1 g10_d2 g10_d3 t0 t2 dt y0_0_0 y0_0_1 theta v_0_0 v_0_1 dW0_0_0 U0_0_0 = a14
  generalize Gen.grad_srk_i_scalar_21_f1_d2_b5abe77cecb9 sqrt f0 f0_d1 f0_d2 f0_d3 f1 f1_d1 f1_d2 f1_d3 g00 g00_d1 g00_d2 g00_d3 g10 g10_d1 g10_d2 g10_d3 t0 t2 dt y0_0_0 y0_0_1 theta v_0_0 v_0_1 dW0_0_0 U0_0_0 = a15
  generalize Gen.grad_srk_i_scalar_21_f1_d3_3fd6413ad5c0 sqrt f0 f0_d1 f0_d2 f0_d3 f1 f1_d1 f1_d2 f1_d3 g00 g00_d1 g00_d2 g00_d3 g10 g10_d1 g10_d2 g10_d3 t0 t2 dt y0_0_0 y0_0_1 theta v_0_0 v_0_1 dW0_0_0 U0_0_0 = a16
  generalize Gen.grad_srk_i_scalar_21_f1_d3_fbd4c7a7e22f sqrt f0 f0_d1 f0_d2 f0_d3 f1 f1_d1 f1_d2 f1_d3 g00 g00_d1 g00_d2 g00_d3 g10 g10_d1 g10_d2 g10_d3 t0 t2 dt y0_0_0 y0_0_1 theta v_0_0 v_0_1 dW0_0_0 U0_0_0 = a17
  generalize Gen.grad_srk_i_scalar_21_f1_d3_fcf23ed257d8 sqrt f0 f0_d1 f0_d2 f0_d3 f1 f1_d1 f1_d2 f1_d3 g00 g00_d1 g00_d2 g00_d3 g10 g10_d1 g10_d2 g10_d3 t0 t2 dt y0_0_0 y0_0_1 theta v_0_0 v_0_1 dW0_0_0 U0_0_0 = a18
  generalize Gen.grad_srk_i_scalar_21_f1_d3_fe887f6a6eb8 sqrt f0 f0_d1 f0_d2 f0_d3 f1 f1_d1 f1_d2 f1_d3 g00 g00_d1 g00_d2 g00_d3 g10 g10_d1 g10_d2 g10_d3 t0 t2 dt y0_0_0 y0_0_1 theta v_0_0 v_0_1 dW0_0_0 U0_0_0 = a19
  generalize Gen.grad_srk_i_scalar_21_g00_d1_5b89d28c8a03 sqrt f0 f0_d1 f0_d2 f0_d3 f1 f1_d1 f1_d2 f1_d3 g00 g00_d1 g00_d2 g00_d3 g10 g10_d1 g10_d2 g10_d3 t0 t2 dt y0_0_0 y0_0_1 theta v_0_0 v_0_1 dW0_0_0 U0_0_0 = a20
  generalize Gen.grad_srk_i_scalar_21_g00_d1_71f3c5419243 sqrt f0 f0_d1 f0_d2 f0_d3 f1 f1_d1 f1_d2 f1_d3 g00 g00_d1 g00_d2 g00_d3 g10 g10_d1 g10_d2 g10_d3 t0 t2 dt y0_0_0 y0_0_1 theta v_0_0 v_0_1 dW0_0_0 U0_0_0 = a21
  generalize Gen.grad_srk_i_scalar_21_g00_d1_e647a8af9478 sqrt f0 f0_d1 f0_d2 f0_d3 f1 f1_d1 f1_d2 f1_d3 g00 g00_d1 g00_d2 g00_d3 g10 g10_d1 g10_d2 g10_d3 t0 t2 dt y0_0_0 y0_0_1 theta v_0_0 v_0_1 dW0_0_0 U0_0_0 = a22
  generalize Gen.grad_srk_i_scalar_21_g00_d2_5d2631134daf sqrt f0 f0_d1 f0_d2 f0_d3 f1 f1_d1 f1_d2 f1_d3 g00 g00_d1 g00_d2 g00_d3 g10 g10_d1 g10_d2 g10_d3 t0 t2 dt y0_0_0 y0_0_1 theta v_0_0 v_0_1 dW0_0_0 U0_0_0 = a23
  generalize Gen.grad_srk_i_scalar_21_g00_d2_766f52bd2357 sqrt f0 f0_d1 f0_d2 f0_d3 f1 f1_d1 f1_d2 f1_d3 g00 g00_d1 g00_d2 g00_d3 g10 g10_d1 g10_d2 g10_d3 t0 t2 dt y0_0_0 y0_0_1 theta v_0_0 v_0_1 dW0_0_0 U0_0_0 = a24
  generalize Gen.grad_srk_i_scalar_21_g00_d2_d550fb212b3b sqrt f0 f0_d1 f0_d2 f0_d3 f1 f1_d1 f1_d2 f1_d3 g00 g00_d1 g00_d2 g00_d3 g10 g10_d1 g10_d2 g10_d3 t0 t2 dt y0_0_0 y0_0_1 theta v_0_0 v_0_1 dW0_0_0 U0_0_0 = a25
  generalize Gen.grad_srk_i_scalar_21_g00_d3_02cc4c085fdc sqrt f0 f0_d1 f0_d2 f0_d3 f1 f1_d1 f1_d2 f1_d3 g00 g00_d1 g00_d2 g00_d3 g10 g10_d1 g10_d2 g10_d3 t0 t2 dt y0_0_0 y0_0_1 theta v_0_0 v_0_1 dW0_0_0 U0_0_0 = a26
  generalize Gen.grad_srk_i_scalar_21_g00_d3_047697ab8737 sqrt f0 f0_d1 f0_d2 f0_d3 f1 f1_d1 f1_d2 f1_d3 g00 g00_d1 g00_d2 g00_d3 g10 g10_d1 g10_d2 g10_d3 t0 t2 dt y0_0_0 y0_0_1 theta v_0_0 v_0_1 dW0_0_0 U0_0_0 = a27
  generalize Gen.grad_srk_i_scalar_21_g00_d3_148212df3a1d sqrt f0 f0_d1 f0_d2 f0_d3 f1 f1_d1 f1_d2 f1_d3 g00 g00_d1 g00_d2 g00_d3 g10 g10_d1 g10_d2 g10_d3 t0 t2 dt y0_0_0 y0_0_1 theta v_0_0 v_0_1 dW0_0_0 U0_0_0 = a28
  generalize Gen.grad_srk_i_scalar_21_g00_d3_ccd0a8aaf4e7 sqrt f0 f0_d1 f0_d2 f0_d3 f1 f1_d1 f1_d2 f1_d3 g00 g00_d1 g00_d2 g00_d3 g10 g10_d1 g10_d2 g10_d3 t0 t2 dt y0_0_0 y0_0_1 theta v_0_0 v_0_1 dW0_0_0 U0_0_0 = a29
  generalize Gen.grad_srk_i_scalar_21_g10_d1_0e530e08d236 sqrt f0 f0_d1 f0_d2 f0_d3 f1 f1_d1 f1_d2 f1_d3 g00 g00_d1 g00_d2 g00_d3 g10 g10_d1 g10_d2 g10_d3 t0 t2 dt y0_0_0 y0_0_1 theta v_0_0 v_0_1 dW0_0_0 U0_0_0 = a30
  generalize Gen.grad_srk_i_scalar_21_g10_d1_38c89ae5f8a2 sqrt f0 f0_d1 f0_d2 f0_d3 f1 f1_d1 f1_d2 f1_d3 g00 g00_d1 g00_d2 g00_d3 g10 g10_d1 g10_d2 g10_d3 t0 t2 dt y0_0_0 y0_0_1 theta v_0_0 v_0_1 dW0_0_0 U0_0_0 = a31
  generalize Gen.grad_srk_i_scalar_21_g10_d1_d2eea7216866 sqrt f0 f0_d1 f0_d2 f0_d3 f1 f1_d1 f1_d2 f1_d3 g00 g00_d1 g00_d2 g00_d3 g10 g10_d1 g10_d2 g10_d3 t0 t2 dt y0_0_0 y0_0_1 theta v_0_0 v_0_1 dW0_0_0 U0_0_0 = a32
  generalize Gen.grad_srk_i_scalar_21_g10_d2_726c7164929d sqrt f0 f0_d1 f0_d2 f0_d3 f1 f1_d1 f1_d2 f1_d3 g00 g00_d1 g00_d2 g00_d3 g10 g10_d1 g10_d2 g10_d3 t0 t2 dt y0_0_0 y0_0_1 theta v_0_0 v_0_1 dW0_0_0 U0_0_0 = a33
  generalize Gen.grad_srk_i_scalar_21_g10_d2_c0c312618872 sqrt f0 f0_d1 f0_d2 f0_d3 f1 f1_d1 f1_d2 f1_d3 g00 g00_d1 g00_d2 g00_d3 g10 g10_d1 g10_d2 g10_d3 t0 t2 dt y0_0_0 y0_0_1 theta v_0_0 v_0_1 dW0_0_0 U0_0_0 = a34
  generalize Gen.grad_srk_i_scalar_21_g10_d2_cb354e0b2055 sqrt f0 f0_d1 f0_d2 f0_d3 f1 f1_d1 f1_d2 f1_d3 g00 g00_d1 g00_d2 g00_d3 g10 g10_d1 g10_d2 g10_d3 t0 t2 dt y0_0_0 y0_0_1 theta v_0_0 v_0_1 dW0_0_0 U0_0_0 = a35
  generalize Gen.grad_srk_i_scalar_21_g10_d3_050ff5f1c731 sqrt f0 f0_d1 f0_d2 f0_d3 f1 f1_d1 f1_d2 f1_d3 g00 g00_d1 g00_d2 g00_d3 g10 g10_d1 g10_d2 g10_d3 t0 t2 dt y0_0_0 y0_0_1 theta v_0_0 v_0_1 dW0_0_0 U0_0_0 = a36
  generalize Gen.grad_srk_i_scalar_21_g10_d3_39dfe1c8a239 sqrt f0 f0_d1 f0_d2 f0_d3 f1 f1_d1 f1_d2 f1_d3 g00 g00_d1 g00_d2 g00_d3 g10 g10_d1 g10_d2 g10_d3 t0 t2 dt y0_0_0 y0_0_1 theta v_0_0 v_0_1 dW0_0_0 U0_0_0 = a37
  generalize Gen.grad_srk_i_scalar_21_g10_d3_4444ea53b757 sqrt f0 f0_d1 f0_d2 f0_d3 f1 f1_d1 f1_d2 f1_d3 g00 g00_d1 g00_d2 g00_d3 g10 g10_d1 g10_d2 g10_d3 t0 t2 dt y0_0_0 y0_0_1 theta v_0_0 v_0_1 dW0_0_0 U0_0_0 = a38
  generalize Gen.grad_srk_i_scalar_21_g10_d3_fc1302f501df sqrt f0 f0_d1 f0_d2 f0_d3 f1 f1_d1 f1_d2 f1_d3 g00 g00_d1 g00_d2 g00_d3 g10 g10_d1 g10_d2 g10_d3 t0 t2 dt y0_0_0 y0_0_1 theta v_0_0 v_0_1 dW0_0_0 U0_0_0 = a39
  ring

set_option maxHeartbeats 4000000 in
/-- `grad_srk_i_scalar_21`: backprop `gy_0_0` = forward derivative `ty_0_0` -/
theorem grad_srk_i_scalar_21_gy_0_0 (sqrt : K → K) (f0 : K → K → K → K → K) (f0_d1 : K → K → K → K → K) (f0_d2 : K → K → K → K → K) (f0_d3 : K → K → K → K → K) (f1 : K → K → K → K → K) (f1_d1 : K → K → K → K → K) (f1_d2 : K → K → K → K → K) (f1_d3 : K → K → K → K → K) (g00 : K → K → K → K → K) (g00_d1 : K → K → K → K → K) (g00_d2 : K → K → K → K → K) (g00_d3 : K → K → K → K → K) (g10 : K → K → K → K → K) (g10_d1 : K → K → K → K → K) (g10_d2 : K → K → K → K → K) (g10_d3 : K → K → K → K → K) (t0 t2 dt y0_0_0 y0_0_1 theta v_0_0 v_0_1 dW0_0_0 U0_0_0 : K) :
    Gen.grad_srk_i_scalar_21_gy_0_0 sqrt f0 f0_d1 f0_d2 f0_d3 f1 f1_d1 f1_d2 f1_d3 g00 g00_d1 g00_d2 g00_d3 g10 g10_d1 g10_d2 g10_d3 t0 t2 dt y0_0_0 y0_0_1 theta v_0_0 v_0_1 dW0_0_0 U0_0_0 = Gen.grad_srk_i_scalar_21_ty_0_0 sqrt f0 f0_d1 f0_d2 f0_d3 f1 f1_d1 f1_d2 f1_d3 g00 g00_d1 g00_d2 g00_d3 g10 g10_d1 g10_d2 g10_d3 t0 t2 dt y0_0_0 y0_0_1 theta v_0_0 v_0_1 dW0_0_0 U0_0_0 := by
  simp only [Gen.grad_srk_i_scalar_21_gy_0_0, Gen.grad_srk_i_scalar_21_ty_0_0]
  generalize Gen.grad_srk_i_scalar_21_f0_d1_048a3ae647bb sqrt f0 f0_d1 f0_d2 f0_d3 f1 f1_d1 f1_d2 f1_d3 g00 g00_d1 g00_d2 g00_d3 g10 g10_d1 g10_d2 g10_d3 t0 t2 dt y0_0_0 y0_0_1 theta v_0_0 v_0_1 dW0_0_0 U0_0_0 = a0
  generalize Gen.grad_srk_i_scalar_21_f0_d1_0d6da03f05d2 sqrt f0 f0_d1 f0_d2 f0_d3 f1 f1_d1 f1_d2 f1_d3 g00 g00_d1 g00_d2 g00_d3 g10 g10_d1 g10_d2 g10_d3 t0 t2 dt y0_0_0 y0_0_1 theta v_0_0 v_0_1 dW0_0_0 U0_0_0 = a1
  generalize Gen.grad_srk_i_scalar_21_f0_d1_ad04c4cfc9dc sqrt f0 f0_d1 f0_d2 f0_d3 f1 f1_d1 f1_d2 f1_d3 g00 g00_d1 g00_d2 g00_d3 g10 g10_d1 g10_d2 g10_d3 t0 t2 dt y0_0_0 y0_0_1 theta v_0_0 v_0_1 dW0_0_0 U0_0_0 = a2
  generalize Gen.grad_srk_i_scalar_21_f0_d1_ec181339d940 sqrt f0 f0_d1 f0_d2 f0_d3 f1 f1_d1 f1_d2 f1_d3 g00 g00_d1 g00_d2 g00_d3 g10 g10_d1 g10_d2 g10_d3 t0 t2 dt y0_0_0 y0_0_1 theta v_0_0 v_0_1 dW0_0_0 U0_0_0 = a3
  generalize Gen.grad_srk_i_scalar_21_f0_d2_325fb4cfeeb2 sqrt f0 f0_d1 f0_d2 f0_d3 f1 f1_d1 f1_d2 f1_d3 g00 g00_d1 g00_d2 g00_d3 g10 g10_d1 g10_d2 g10_d3 t0 t2 dt y0_0_0 y0_0_1 theta v_0_0 v_0_1 dW0_0_0 U0_0_0 = a4
  generalize Gen.grad_srk_i_scalar_21_f0_d2_78a5f58013c7 sqrt f0 f0_d1 f0_d2 f0_d3 f1 f1_d1 f1_d2 f1_d3 g00 g00_d1 g00_d2 g00_d3 g10 g10_d1 g10_d2 g10_d3 t0 t2 dt y0_0_0 y0_0_1 theta v_0_0 v_0_1 dW0_0_0 U0_0_0 = a5
  generalize Gen.grad_srk_i_scalar_21_f0_d2_ccf1535f12fd sqrt f0 f0_d1 f0_d2 f0_d3 f1 f1_d1 f1_d2 f1_d3 g00 g00_d1 g00_d2 g00_d3 g10 g10_d1 g10_d2 g10_d3 t0 t2 dt y0_0_0 y0_0_1 theta v_0_0 v_0_1 dW0_0_0 U0_0_0 = a6
  generalize Gen.grad_srk_i_scalar_21_f1_d1_11f8b33c18d7 sqrt f0 f0_d1 f0_d2 f0_d3 f1 f1_d1 f1_d2 f1_d3 g00 g00_d1 g00_d2 g00_d3 g10 g10_d1 g10_d2 g10_d3 t0 t2 dt y0_0_0 y0_0_1 theta v_0_0 v_0_1 dW0_0_0 U0_0_0 = a7
  generalize Gen.grad_srk_i_scalar_21_f1_d1_7db86f6d49e8 sqrt f0 f0_d1 f0_d2 f0_d3 f1 f1_d1 f1_d2 f1_d3 g00 g00_d1 g00_d2 g00_d3 g10 g10_d1 g10_d2 g10_d3 t0 t2 dt y0_0_0 y0_0_1 theta v_0_0 v_0_1 dW0_0_0 U0_0_0 = a8
  generalize Gen.grad_srk_i_scalar_21_f1_d1_b5359770c025 sqrt f0 f0_d1 f0_d2 f0_d3 f1 f1_d1 f1_d2 f1_d3 g00 g00_d1 g00_d2 g00_d3 g10 g10_d1 g10_d2 g10_d3 t0 t2 dt y0_0_0 y0_0_1 theta v_0_0 v_0_1 dW0_0_0 U0_0_0 = a9
  generalize Gen.grad_srk_i_scalar_21_f1_d1_bf7375131e55 sqrt f0 f0_d1 f0_d2 f0_d3 f1 f1_d1 f1_d2 f1_d3 g00 g00_d1 g00_d2 g00_d3 g10 g10_d1 g10_d2 g10_d3 t0 t2 dt y0_0_0 y0_0_1 theta v_0_0 v_0_1 dW0_0_0 U0_0_0 = a10
  generalize Gen.grad_srk_i_scalar_21_f1_d2_25f7e10acdf7 sqrt f0 f0_d1 f0_d2 f0_d3 f1 f1_d1 f1_d2 f1_d3 g00 g00_d1 g00_d2 g00_d3 g10 g10_d1 g10_d2 g10_d3 t0 t2 dt y0_0_0 y0_0_1 theta v_0_0 v_0_1 dW0_0_0 U0_0_0 = a11
  generalize Gen.grad_srk_i_scalar_21_f1_d2_79b001e662ef sqrt f0 f0_d1 f0_d2 f0_d3 f1 f1_d1 f1_d2 f1_d3 g00 g00_d1 g00_d2 g00_d3 g10 g10_d1 g10_d2 g10_d3 t0 t2 dt y0_0_0 y0_0_1 theta v_0_0 v_0_1 dW0_0_0 U0_0_0 = a12
  generalize Gen.grad_srk_i_scalar_21_f1_d2_b5abe77cecb9 sqrt f0 f0_d1 f0_d2 f0_d3 f1 f1_d1 f1_d2 f1_d3 g00 g00_d1 g00_d2 g00_d3 g10 g10_d1 g10_d2 g10_d3 t0 t2 dt y0_0_0 y0_0_1 theta v_0_0 v_0_1 dW0_0_0 U0_0_0 = a13
  generalize Gen.grad_srk_i_scalar_21_g00_d1_5b89d28c8a03 sqrt f0 f0_d1 f0_d2 f0_d3 f1 f1_d1 f1_d2 f1_d3 g00 g00_d1 g00_d2 g00_d3 g10 g10_d1 g10_d2 g10_d3 t0 t2 dt y0_0_0 y0_0_1 theta v_0_0 v_0_1 dW0_0_0 U0_0_0 = a14
  generalize Gen.grad_srk_i_scalar_21_g00_d1_71f3c5419243 sqrt f0 f0_d1 f0_d2 f0_d3 f1 f1_d1 f1_d2 f1_d3 g00 g00_d1 g00_d2 g00_d3 g10 g10_d1 g10_d2 g10_d3 t0 t2 dt y0_0_0 y0_0_1 theta v_0_0 v_0_1 dW0_0_0 U0_0_0 = a15
  generalize Gen.grad_srk_i_scalar_21_g00_d1_b079f164c7e7 sqrt f0 f0_d1 f0_d2 f0_d3 f1 f1_d1 f1_d2 f1_d3 g00 g00_d1 g00_d2 g00_d3 g10 g10_d1 g10_d2 g10_d3 t0 t2 dt y0_0_0 y0_0_1 theta v_0_0 v_0_1 dW0_0_0 U0_0_0 = a16
  generalize Gen.grad_srk_i_scalar_21_g00_d1_e647a8af9478 sqrt f0 f0_d1 f0_d2 f0_d3 f1 f1_d1 f1_d2 f1_d3 g00 g00_d1 g00_d2 g00_d3 g10 g10_d1 g10_d2 g10_d3 t0 t2 dt y0_0_0 y0_0_1 theta v_0_0 v_0_1 dW0_0_0 U0_0_0 = a17
  generalize Gen.grad_srk_i_scalar_21_g00_d2_5d2631134daf sqrt f0 f0_d1 f0_d2 f0_d3 f1 f1_d1 f1_d2 f1_d3 g00 g00_d1 g00_d2 g00_d3 g10 g10_d1 g10_d2 g10_d3 t0 t2 dt y0_0_0 y0_0_1 theta v_0_0 v_0_1 dW0_0_0 U0_0_0 = a18
  generalize Gen.grad_srk_i_scalar_21_g00_d2_766f52bd2357 sqrt f0 f0_d1 f0_d2 f0_d3 f1 f1_d1 f1_d2 f1_d3 g00 g00_d1 g00_d2 g00_d3 g10 g10_d1 g10_d2 g10_d3 t0 t2 dt y0_0_0 y0_0_1 theta v_0_0 v_0_1 dW0_0_0 U0_0_0 = a19
  generalize Gen.grad_srk_i_scalar_21_g00_d2_d550fb212b3b sqrt f0 f0_d1 f0_d2 f0_d3 f1 f1_d1 f1_d2 f1_d3 g00 g00_d1 g00_d2 g00_d3 g10 g10_d1 g10_d2 g10_d3 t0 t2 dt y0_0_0 y0_0_1 theta v_0_0 v_0_1 dW0_0_0 U0_0_0 = a20
  generalize Gen.grad_srk_i_scalar_21_g10_d1_0e530e08d236 sqrt f0 f0_d1 f0_d2 f0_d3 f1 f1_d1 f1_d2 f1_d3 g00 g00_d1 g00_d2 g00_d3 g10 g10_d1 g10_d2 g10_d3 t0 t2 dt y0_0_0 y0_0_1 theta v_0_0 v_0_1 dW0_0_0 U0_0_0 = a21
  generalize Gen.grad_srk_i_scalar_21_g10_d1_38c89ae5f8a2 sqrt f0 f0_d1 f0_d2 f0_d3 f1 f1_d1 f1_d2 f1_d3 g00 g00_d1 g00_d2 g00_d3 g10 g10_d1 g10_d2 g10_d3 t0 t2 dt y0_0_0 y0_0_1 theta v_0_0 v_0_1 dW0_0_0 U0_0_0 = a22
  generalize Gen.grad_srk_i_scalar_21_g10_d1_61f9a6123158 sqrt f0 f0_d1 f0_d2 f0_d3 f1 f1_d1 f1_d2 f1_d3 g00 g00_d1 g00_d2 g00_d3 g10 g10_d1 g10_d2 g10_d3 t0 t2 dt y0_0_0 y0_0_1 theta v_0_0 v_0_1 dW0_0_0 U0_0_0 = a23
  generalize Gen.grad_srk_i_scalar_21_g10_d1_d2eea7216866 sqrt f0 f0_d1 f0_d2 f0_d3 f1 f1_d1 f1_d2 f1_d3 g00 g00_d1 g00_d2 g00_d3 g10 g10_d1 g10_d2 g10_d3 t0 t2 dt y0_0_0 y0_0_1 theta v_0_0 v_0_1 dW0_0_0 U0_0_0 = a24
  generalize Gen.grad_srk_i_scalar_21_g10_d2_726c7164929d sqrt f0 f0_d1 f0_d2 f0_d3 f1 f1_d1 f1_d2 f1_d3 g00 g00_d1 g00_d2 g00_d3 g10 g10_d1 g10_d2 g10_d3 t0 t2 dt y0_0_0 y0_0_1 theta v_0_0 v_0_1 dW0_0_0 U0_0_0 = a25
  generalize Gen.grad_srk_i_scalar_21_g10_d2_c0c312618872 sqrt f0 f0_d1 f0_d2 f0_d3 f1 f1_d1 f1_d2 f1_d3 g00 g00_d1 g00_d2 g00_d3 g10 g10_d1 g10_d2 g10_d3 t0 t2 dt y0_0_0 y0_0_1 theta v_0_0 v_0_1 dW0_0_0 U0_0_0 = a26
  generalize Gen.grad_srk_i_scalar_21_g10_d2_cb354e0b2055 sqrt f0 f0_d1 f0_d2 f0_d3 f1 f1_d1 f1_d2 f1_d3 g00 g00_d1 g00_d2 g00_d3 g10 g10_d1 g10_d2 g10_d3 t0 t2 dt y0_0_0 y0_0_1 theta v_0_0 v_0_1 dW0_0_0 U0_0_0 = a27
  ring

set_option maxHeartbeats 4000000 in
/-- `grad_srk_i_scalar_21`: backprop `gy_0_1` = forward derivative `ty_0_1` -/
theorem grad_srk_i_scalar_21_gy_0_1 (sqrt : K → K) (f0 : K → K → K → K → K) (f0_d1 : K → K → K → K → K) (f0_d2 : K → K → K → K → K) (f0_d3 : K → K → K → K → K) (f1 : K → K → K → K → K) (f1_d1 : K → K → K → K → K) (f1_d2 : K → K → K → K → K) (f1_d3 : K → K → K → K → K) (g00 : K → K → K → K → K) (g00_d1 : K → K → K → K → K) (g00_d2 : K → K → K → K → K) (g00_d3 : K → K → K → K → K) (g10 : K → K → K → K → K) (g10_d1 : K → K → K → K → K) (g10_d2 : K → K → K → K → K) (g10_d3 : K → K → K → K → K) (t0 t2 dt y0_0_0 y0_0_1 theta v_0_0 v_0_1 dW0_0_0 U0_0_0 : K) :
    Gen.grad_srk_i_scalar_21_gy_0_1 sqrt f0 f0_d1 f0_d2 f0_d3 f1 f1_d1 f1_d2 f1_d3 g00 g00_d1 g00_d2 g00_d3 g10 g10_d1 g10_d2 g10_d3 t0 t2 dt y0_0_0 y0_0_1 theta v_0_0 v_0_1 dW0_0_0 U0_0_0 = Gen.grad_srk_i_scalar_21_ty_0_1 sqrt f0 f0_d1 f0_d2 f0_d3 f1 f1_d1 f1_d2 f1_d3 g00 g00_d1 g00_d2 g00_d3 g10 g10_d1 g10_d2 g10_d3 t0 t2 dt y0_0_0 y0_0_1 theta v_0_0 v_0_1 dW0_0_0 U0_0_0 := by
  simp only [Gen.grad_srk_i_scalar_21_gy_0_1, Gen.grad_srk_i_scalar_21_ty_0_1]
  generalize Gen.grad_srk_i_scalar_21_f0_d1_048a3ae647bb sqrt f0 f0_d1 f0_d2 f0_d3 f1 f1_d1 f1_d2 f1_d3 g00 g00_d1 g00_d2 g00_d3 g10 g10_d1 g10_d2 g10_d3 t0 t2 dt y0_0_0 y0_0_1 theta v_0_0 v_0_1 dW0_0_0 U0_0_0 = a0
  generalize Gen.grad_srk_i_scalar_21_f0_d1_0d6da03f05d2 sqrt f0 f0_d1 f0_d2 f0_d3 f1 f1_d1 f1_d2 f1_d3 g00 g00_d1 g00_d2 g00_d3 g10 g10_d1 g10_d2 g10_d3 t0 t2 dt y0_0_0 y0_0_1 theta v_0_0 v_0_1 dW0_0_0 U0_0_0 = a1
  generalize Gen.grad_srk_i_scalar_21_f0_d1_ec181339d940 sqrt f0 f0_d1 f0_d2 f0_d3 f1 f1_d1 f1_d2 f1_d3 g00 g00_d1 g00_d2 g00_d3 g10 g10_d1 g10_d2 g10_d3 t0 t2 dt y0_0_0 y0_0_1 theta v_0_0 v_0_1 dW0_0_0 U0_0_0 = a2
  generalize Gen.grad_srk_i_scalar_21_f0_d2_325fb4cfeeb2 sqrt f0 f0_d1 f0_d2 f0_d3 f1 f1_d1 f1_d2 f1_d3 g00 g00_d1 g00_d2 g00_d3 g10 g10_d1 g10_d2 g10_d3 t0 t2 dt y0_0_0 y0_0_1 theta v_0_0 v_0_1 dW0_0_0 U0_0_0 = a3
  generalize Gen.grad_srk_i_scalar_21_f0_d2_78a5f58013c7 sqrt f0 f0_d1 f0_d2 f0_d3 f1 f1_d1 f1_d2 f1_d3 g00 g00_d1 g00_d2 g00_d3 g10 g10_d1 g10_d2 g10_d3 t0 t2 dt y0_0_0 y0_0_1 theta v_0_0 v_0_1 dW0_0_0 U0_0_0 = a4
  generalize Gen.grad_srk_i_scalar_21_f0_d2_78e8b9d07752 sqrt f0 f0_d1 f0_d2 f0_d3 f1 f1_d1 f1_d2 f1_d3 g00 g00_d1 g00_d2 g00_d3 g10 g10_d1 g10_d2 g10_d3 t0 t2 dt y0_0_0 y0_0_1 theta v_0_0 v_0_1 dW0_0_0 U0_0_0 = a5
  generalize Gen.grad_srk_i_scalar_21_f0_d2_ccf1535f12fd sqrt f0 f0_d1 f0_d2 f0_d3 f1 f1_d1 f1_d2 f1_d3 g00 g00_d1 g00_d2 g00_d3 g10 g10_d1 g10_d2 g10_d3 t0 t2 dt y0_0_0 y0_0_1 theta v_0_0 v_0_1 dW0_0_0 U0_0_0 = a6
  generalize Gen.grad_srk_i_scalar_21_f1_d1_11f8b33c18d7 sqrt f0 f0_d1 f0_d2 f0_d3 f1 f1_d1 f1_d2 f1_d3 g00 g00_d1 g00_d2 g00_d3 g10 g10_d1 g10_d2 g10_d3 t0 t2 dt y0_0_0 y0_0_1 theta v_0_0 v_0_1 dW0_0_0 U0_0_0 = a7
  generalize Gen.grad_srk_i_scalar_21_f1_d1_7db86f6d49e8 sqrt f0 f0_d1 f0_d2 f0_d3 f1 f1_d1 f1_d2 f1_d3 g00 g00_d1 g00_d2 g00_d3 g10 g10_d1 g10_d2 g10_d3 t0 t2 dt y0_0_0 y0_0_1 theta v_0_0 v_0_1 dW0_0_0 U0_0_0 = a8
  generalize Gen.grad_srk_i_scalar_21_f1_d1_bf7375131e55 sqrt f0 f0_d1 f0_d2 f0_d3 f1 f1_d1 f1_d2 f1_d3 g00 g00_d1 g00_d2 g00_d3 g10 g10_d1 g10_d2 g10_d3 t0 t2 dt y0_0_0 y0_0_1 theta v_0_0 v_0_1 dW0_0_0 U0_0_0 = a9
  generalize Gen.grad_srk_i_scalar_21_f1_d2_11156d5faf62 sqrt f0 f0_d1 f0_d2 f0_d3 f1 f1_d1 f1_d2 f1_d3 g00 g00_d1 g00_d2 g00_d3 g10 g10_d1 g10_d2 g10_d3 t0 t2 dt y0_0_0 y0_0_1 theta v_0_0 v_0_1 dW0_0_0 U0_0_0 = a10
  generalize Gen.grad_srk_i_scalar_21_f1_d2_25f7e10acdf7 sqrt f0 f0_d1 f0_d2 f0_d3 f1 f1_d1 f1_d2 f1_d3 g00 g00_d1 g00_d2 g00_d3 g10 g10_d1 g10_d2 g10_d3 t0 t2 dt y0_0_0 y0_0_1 theta v_0_0 v_0_1 dW0_0_0 U0_0_0 = a11
  generalize Gen.grad_srk_i_scalar_21_f1_d2_79b001e662ef sqrt f0 f0_d1 f0_d2 f0_d3 f1 f1_d1 f1_d2 f1_d3 g00 g00_d1 g00_d2 g00_d3 g10 g10_d1 g10_d2 g10_d3 t0 t2 dt y0_0_0 y0_0_1 theta v_0_0 v_0_1 dW0_0_0 U0_0_0 = a12
  generalize Gen.grad_srk_i_scalar_21_f1_d2_b5abe77cecb9 sqrt f0 f0_d1 f0_d2 f0_d3 f1 f1_d1 f1_d2 f1_d3 g00 g00_d1 g00_d2 g00_d3 g10 g10_d1 g10_d2 g10_d3 t0 t2 dt y0_0_0 y0_0_1 theta v_0_0 v_0_1 dW0_0_0 U0_0_0 = a13
  generalize Gen.grad_srk_i_scalar_21_g00_d1_5b89d28c8a03 sqrt f0 f0_d1 f0_d2 f0_d3 f1 f1_d1 f1_d2 f1_d3 g00 g00_d1 g00_d2 g00_d3 g10 g10_d1 g10_d2 g10_d3 t0 t2 dt y0_0_0 y0_0_1 theta v_0_0 v_0_1 dW0_0_0 U0_0_0 = a14
  generalize Gen.grad_srk_i_scalar_21_g00_d1_71f3c5419243 sqrt f0 f0_d1 f0_d2 f0_d3 f1 f1_d1 f1_d2 f1_d3 g00 g00_d1 g00_d2 g00_d3 g10 g10_d1 g10_d2 g10_d3 t0 t2 dt y0_0_0 y0_0_1 theta v_0_0 v_0_1 dW0_0_0 U0_0_0 = a15
  generalize Gen.grad_srk_i_scalar_21_g00_d1_e647a8af9478 sqrt f0 f0_d1 f0_d2 f0_d3 f1 f1_d1 f1_d2 f1_d3 g00 g00_d1 g00_d2 g00_d3 g10 g10_d1 g10_d2 g10_d3 t0 t2 dt y0_0_0 y0_0_1 theta v_0_0 v_0_1 dW0_0_0 U0_0_0 = a16
  generalize Gen.grad_srk_i_scalar_21_g00_d2_5d2631134daf sqrt f0 f0_d1 f0_d2 f0_d3 f1 f1_d1 f1_d2 f1_d3 g00 g00_d1 g00_d2 g00_d3 g10 g10_d1 g10_d2 g10_d3 t0 t2 dt y0_0_0 y0_0_1 theta v_0_0 v_0_1 dW0_0_0 U0_0_0 = a17
  generalize Gen.grad_srk_i_scalar_21_g00_d2_766f52bd2357 sqrt f0 f0_d1 f0_d2 f0_d3 f1 f1_d1 f1_d2 f1_d3 g00 g00_d1 g00_d2 g00_d3 g10 g10_d1 g10_d2 g10_d3 t0 t2 dt y0_0_0 y0_0_1 theta v_0_0 v_0_1 dW0_0_0 U0_0_0 = a18
  generalize Gen.grad_srk_i_scalar_21_g00_d2_8021045b73b0 sqrt f0 f0_d1 f0_d2 f0_d3 f1 f1_d1 f1_d2 f1_d3 g00 g00_d1 g00_d2 g00_d3 g10 g10_d1 g10_d2 g10_d3 t0 t2 dt y0_0_0 y0_0_1 theta v_0_0 v_0_1 dW0_0_0 U0_0_0 = a19
  generalize Gen.grad_srk_i_scalar_21_g00_d2_d550fb212b3b sqrt f0 f0_d1 f0_d2 f0_d3 f1 f1_d1 f1_d2 f1_d3 g00 g00_d1 g00_d2 g00_d3 g10 g10_d1 g10_d2 g10_d3 t0 t2 dt y0_0_0 y0_0_1 theta v_0_0 v_0_1 dW0_0_0 U0_0_0 = a20
  generalize Gen.grad_srk_i_scalar_21_g10_d1_0e530e08d236 sqrt f0 f0_d1 f0_d2 f0_d3 f1 f1_d1 f1_d2 f1_d3 g00 g00_d1 g00_d2 g00_d3 g10 g10_d1 g10_d2 g10_d3 t0 t2 dt y0_0_0 y0_0_1 theta v_0_0 v_0_1 dW0_0_0 U0_0_0 = a21
  generalize Gen.grad_srk_i_scalar_21_g10_d1_38c89ae5f8a2 sqrt f0 f0_d1 f0_d2 f0_d3 f1 f1_d1 f1_d2 f1_d3 g00 g00_d1 g00_d2 g00_d3 g10 g10_d1 g10_d2 g10_d3 t0 t2 dt y0_0_0 y0_0_1 theta v_0_0 v_0_1 dW0_0_0 U0_0_0 = a22
  generalize Gen.grad_srk_i_scalar_21_g10_d1_d2eea7216866 sqrt f0 f0_d1 f0_d2 f0_d3 f1 f1_d1 f1_d2 f1_d3 g00 g00_d1 g00_d2 g00_d3 g10 g10_d1 g10_d2 g10_d3 t0 t2 dt y0_0_0 y0_0_1 theta v_0_0 v_0_1 dW0_0_0 U0_0_0 = a23
  generalize Gen.grad_srk_i_scalar_21_g10_d2_726c7164929d sqrt f0 f0_d1 f0_d2 f0_d3 f1 f1_d1 f1_d2 f1_d3 g00 g00_d1 g00_d2 g00_d3 g10 g10_d1 g10_d2 g10_d3 t0 t2 dt y0_0_0 y0_0_1 theta v_0_0 v_0_1 dW0_0_0 U0_0_0 = a24
  generalize Gen.grad_srk_i_scalar_21_g10_d2_a90e0cad5787 sqrt f0 f0_d1 f0_d2 f0_d3 f1 f1_d1 f1_d2 f1_d3 g00 g00_d1 g00_d2 g00_d3 g10 g10_d1 g10_d2 g10_d3 t0 t2 dt y0_0_0 y0_0_1 theta v_0_0 v_0_1 dW0_0_0 U0_0_0 = a25
  generalize Gen.grad_srk_i_scalar_21_g10_d2_c0c312618872 sqrt f0 f0_d1 f0_d2 f0_d3 f1 f1_d1 f1_d2 f1_d3 g00 g00_d1 g00_d2 g00_d3 g10 g10_d1 g10_d2 g10_d3 t0 t2 dt y0_0_0 y0_0_1 theta v_0_0 v_0_1 dW0_0_0 U0_0_0 = a26
  generalize Gen.grad_srk_i_scalar_21_g10_d2_cb354e0b2055 sqrt f0 f0_d1 f0_d2 f0_d3 f1 f1_d1 f1_d2 f1_d3 g00 g00_d1 g00_d2 g00_d3 g10 g10_d1 g10_d2 g10_d3 t0 t2 dt y0_0_0 y0_0_1 theta v_0_0 v_0_1 dW0_0_0 U0_0_0 = a27
  ring

end C08
