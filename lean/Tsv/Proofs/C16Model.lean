/-
C16, part B — which method each solver needs, and that a missing one is an explicit error.

`Model.Iface` (hand-written) = the registration rules of `ForwardSDE.__init__` + check_contract's has_f / has_g;
`Gen.IfaceTables` (regenerated on every run) = `needs`: the ForwardSDE entry points each solver's
init_extra_solver_state + step call, obtained by instrumenting a real step; `supported`; and `traced`: the outcome of the
symbolic step of every interface cell of part A (ok, or RuntimeError naming the method).

All theorems are closed by kernel evaluation (`decide`) over ALL 32 presence patterns x 11 solvers x 4 noise types.
The values of the steps that are `ok` are equal to those of the (f, g) interface by Proofs/C16.lean (part A); the model
itself is tied to the real `sdeint` by the exhaustive enumeration in vlib/props/c16.py (Drivers/IfaceMain.lean).
-/
import Tsv.Model.Iface
import Tsv.Gen.IfaceTables

namespace C16Model
open Model.Iface Gen.IfaceTables

/-- A step is defined exactly when every entry point the solver calls is callable. -/
theorem step_defined_iff :
    ∀ p ∈ Pres.all, ∀ s ∈ Solver.all, ∀ n ∈ Noise.all,
      (stepOutcome p n (needs s n) = .ok ↔ ∀ e ∈ needs s n, callable p n e = true) := by
  decide

/-- Otherwise the outcome is the RuntimeError naming a method (`f` or `g`) that the user did NOT supply - never a value. -/
theorem missing_method_errors :
    ∀ p ∈ Pres.all, ∀ s ∈ Solver.all, ∀ n ∈ Noise.all,
      (¬ ∀ e ∈ needs s n, callable p n e = true) →
      ∃ m ∈ [Meth.f, Meth.g], stepOutcome p n (needs s n) = .missing m ∧ p.has m = false := by
  decide

/-- The error names the FIRST entry point, in call order, that is not callable (nothing is computed past it). -/
theorem error_is_first_failing_call :
    ∀ p ∈ Pres.all, ∀ s ∈ Solver.all, ∀ n ∈ Noise.all,
      stepOutcome p n (needs s n) = ((needs s n).find? (fun e => !callable p n e)).elim .ok (call p n) := by
  decide

/-- `sdeint` as a whole: ok / ValueError (contract) / RuntimeError (missing method) and nothing else; ok iff accepted by the
contract and sufficient for the solver. -/
theorem sdeint_ok_iff :
    ∀ p ∈ Pres.all, ∀ s ∈ Solver.all, ∀ n ∈ Noise.all,
      (sdeintResult p n (needs s n) = .ok ↔ (acceptedByContract p = true ∧ sufficient p n (needs s n) = true)) := by
  decide

/-- Interface invariance: two accepted patterns that are both sufficient for a solver both integrate (and then give the
values of the (f, g) interface: part A). -/
theorem interface_invariance (p q : Pres) (s : Solver) (n : Noise)
    (hp : acceptedByContract p = true) (hq : acceptedByContract q = true)
    (sp : sufficient p n (needs s n) = true) (sq : sufficient q n (needs s n) = true) :
    sdeintResult p n (needs s n) = .ok ∧ sdeintResult q n (needs s n) = .ok :=
  ⟨(sdeint_ok_iff p (Pres.all_complete p) s (Solver.all_complete s) n (Noise.all_complete n)).2 ⟨hp, sp⟩,
   (sdeint_ok_iff q (Pres.all_complete q) s (Solver.all_complete s) n (Noise.all_complete n)).2 ⟨hq, sq⟩⟩

/-- The plain (f, g) interface - and anything containing it - is sufficient for every solver on every supported noise type. -/
theorem f_and_g_methods_always_suffice :
    ∀ p ∈ Pres.all, p.f = true → p.g = true → ∀ s ∈ Solver.all, ∀ n ∈ Noise.all,
      sdeintResult p n (needs s n) = .ok := by
  decide

/-- A solver that is supported calls something; an unsupported one has no step. -/
theorem needs_nonempty_iff_supported :
    ∀ s ∈ Solver.all, ∀ n ∈ Noise.all, (supported s n = true ↔ needs s n ≠ []) := by
  decide

/-- The regenerated symbolic steps of part A agree with the model: a traced cell integrates / raises `missing m` exactly
as `stepOutcome` says for the methods its user object has. -/
theorem traced_cells_agree_with_model :
    ∀ c ∈ traced, stepOutcome c.2.2.1 c.2.1 (needs c.1 c.2.1) = c.2.2.2 := by
  decide +kernel

/-- every traced cell belongs to a supported (solver, noise) pair, and the baseline of every such cell is traced -/
theorem traced_cells_supported : ∀ c ∈ traced, supported c.1 c.2.1 = true := by
  decide +kernel

/-- The six variants documented in tests/test_sdeint.py (general noise):
(f,g) · f_and_g · (f,g_prod) · f_and_g_prod · (f_and_g,g_prod) · (f,f_and_g,g_prod): which solvers accept them. -/
theorem documented_six_general :
    [(⟨true, true, false, false, false⟩ : Pres), ⟨false, false, true, false, false⟩, ⟨true, false, false, true, false⟩,
     ⟨false, false, false, false, true⟩, ⟨false, false, true, true, false⟩, ⟨true, false, true, true, false⟩].map
      (fun p => [Solver.euler_i, .euler_heun_s, .heun_s, .midpoint_s, .log_ode_s, .reversible_heun_s].map
        (fun s => (sdeintResult p .general (needs s .general)).name))
    = [["ok", "ok", "ok", "ok", "ok", "ok"],
       ["ok", "RuntimeError:g", "ok", "ok", "RuntimeError:g", "ok"],
       ["ok", "ok", "ok", "ok", "RuntimeError:g", "RuntimeError:g"],
       ["ok", "RuntimeError:g", "ok", "ok", "RuntimeError:g", "RuntimeError:f"],
       ["ok", "ok", "ok", "ok", "RuntimeError:g", "ok"],
       ["ok", "ok", "ok", "ok", "RuntimeError:g", "ok"]] := by
  decide

end C16Model
