/-
Core lemmas about the Brownian tree model (`Model/Brownian.lean`): well-formedness, refinement, and the fact that the
search `loc` returns exactly what the split-free search `find` returns on the final tree — from which stability of the
located pieces under later refinement and from any search start follows.  Shared by C03, C05, C06, C07.

Times form an arbitrary linear order, `c.lt`/`c.eq` are its `<`/`=`, `rnd` is an arbitrary idempotent map; values are
completely abstract.  Non-dyadic mode (`halfway = false`) throughout this file.
-/
import Tsv.Model.Brownian
import Mathlib.Order.Defs.LinearOrder
import Mathlib.Order.Basic
import Mathlib.Data.List.Basic
import Mathlib.Tactic.Common

namespace BMCore
open Model.BM

variable {T : Type} [LinearOrder T]

/-- the configuration's comparisons are the order's -/
structure Sound (c : Cfg T) : Prop where
  lt : ∀ a b, c.lt a b = decide (a < b)
  eq : ∀ a b, c.eq a b = decide (a = b)
  rnd_idem : ∀ x, c.rnd (c.rnd x) = c.rnd x
  nohalf : c.halfway = false

/-- children partition the parent, strictly; every mid point is a resolved (rounded) time -/
def WF (c : Cfg T) : Tree T → Prop
  | Tree.leaf s e => s < e
  | Tree.node s e m l r => s < m ∧ m < e ∧ c.rnd m = m ∧ l.s = s ∧ l.e = m ∧ r.s = m ∧ r.e = e ∧ WF c l ∧ WF c r

/-- `t'` is `t` with some leaves replaced by subtrees over the same interval -/
def Refines : Tree T → Tree T → Prop
  | Tree.leaf s e, t' => t'.s = s ∧ t'.e = e
  | Tree.node s e m l r, Tree.node s' e' m' l' r' => s' = s ∧ e' = e ∧ m' = m ∧ Refines l l' ∧ Refines r r'
  | Tree.node _ _ _ _ _, Tree.leaf _ _ => False

theorem Refines.refl : ∀ t : Tree T, Refines t t
  | Tree.leaf _ _ => ⟨rfl, rfl⟩
  | Tree.node _ _ _ l r => ⟨rfl, rfl, rfl, Refines.refl l, Refines.refl r⟩

theorem Refines.bounds : ∀ {t t' : Tree T}, Refines t t' → t'.s = t.s ∧ t'.e = t.e
  | Tree.leaf _ _, _, h => h
  | Tree.node _ _ _ _ _, Tree.node _ _ _ _ _, h => ⟨h.1, h.2.1⟩
  | Tree.node _ _ _ _ _, Tree.leaf _ _, h => h.elim

theorem Refines.trans : ∀ {a b c : Tree T}, Refines a b → Refines b c → Refines a c
  | Tree.leaf _ _, _, _, h1, h2 => ⟨h2.bounds.1.trans h1.1, h2.bounds.2.trans h1.2⟩
  | Tree.node _ _ _ _ _, Tree.node _ _ _ _ _, Tree.node _ _ _ _ _, h1, h2 =>
      ⟨h2.1.trans h1.1, h2.2.1.trans h1.2.1, h2.2.2.1.trans h1.2.2.1, h1.2.2.2.1.trans h2.2.2.2.1,
        h1.2.2.2.2.trans h2.2.2.2.2⟩
  | Tree.node _ _ _ _ _, Tree.node _ _ _ _ _, Tree.leaf _ _, _, h2 => h2.elim
  | Tree.node _ _ _ _ _, Tree.leaf _ _, _, h1, _ => h1.elim

/-- the split-free search: the nodes of `t` that tile `[ta, tb]` the way `_loc_inner` walks -/
def find : Tree T → T → T → Option (List Path)
  | Tree.leaf s e, ta, tb => if ta = s ∧ tb = e then some [[]] else none
  | Tree.node s e m l r, ta, tb =>
    if ta = s ∧ tb = e then some [[]]
    else if tb ≤ m then (find l ta tb).map (·.map (false :: ·))
    else if m ≤ ta then (find r ta tb).map (·.map (true :: ·))
    else
      match find l ta m, find r m tb with
      | some a, some b => some (a.map (false :: ·) ++ b.map (true :: ·))
      | _, _ => none

/-- pieces found once are found again, unchanged, in every refinement of the tree -/
theorem find_refines : ∀ {t t' : Tree T} {ta tb : T} {ps}, find t ta tb = some ps → Refines t t' →
    find t' ta tb = some ps
  | Tree.leaf s e, t', ta, tb, ps, h, hr => by
      simp only [find] at h
      split at h
      · rename_i hm
        cases t' with
        | leaf s' e' => simp only [find]; obtain ⟨h1, h2⟩ := hr; simp only [Tree.s, Tree.e] at h1 h2; simp [h1, h2, hm, h]
        | node s' e' m' l' r' =>
            simp only [find]; obtain ⟨h1, h2⟩ := hr; simp only [Tree.s, Tree.e] at h1 h2; simp [h1, h2, hm, h]
      · simp at h
  | Tree.node s e m l r, Tree.leaf _ _, _, _, _, _, hr => hr.elim
  | Tree.node s e m l r, Tree.node s' e' m' l' r', ta, tb, ps, h, hr => by
      obtain ⟨rfl, rfl, rfl, hl, hrr⟩ := hr
      simp only [find] at h ⊢
      split
      · rename_i hm; simpa [hm] using h
      · rename_i hm
        simp only [hm, if_false] at h
        split
        · rename_i h1
          simp only [h1, if_true] at h
          cases hf : find l ta tb with
          | none => simp [hf] at h
          | some a => rw [find_refines hf hl]; simpa [hf] using h
        · rename_i h1
          simp only [h1, if_false] at h
          split
          · rename_i h2
            simp only [h2, if_true] at h
            cases hf : find r ta tb with
            | none => simp [hf] at h
            | some a => rw [find_refines hf hrr]; simpa [hf] using h
          · rename_i h2
            simp only [h2, if_false] at h
            split at h
            · rename_i a b hf1 hf2
              rw [find_refines hf1 hl, find_refines hf2 hrr]
              simpa using h
            · simp at h

/-! ### `locDown` -/

variable {c : Cfg T}

theorem split_spec (hc : Sound c) (fuel : Nat) (s e x : T) (hx : c.rnd x = x) {t' d}
    (h : split c fuel s e x = some (t', d)) : t' = Tree.node s e x (Tree.leaf s x) (Tree.leaf x e) := by
  simp only [split, hc.nohalf, Bool.false_eq_true, if_false, Option.some.injEq, Prod.mk.injEq] at h
  rw [← h.1, splitExact, hx]

/-- `locDown` only refines, keeps strict well-formedness, and returns what `find` finds afterwards -/
theorem locDown_spec (hc : Sound c) : ∀ (fuel : Nat) (t : Tree T) (ta tb : T) {t' ps d},
    locDown c fuel t ta tb = some (t', ps, d) → WF c t → t.s ≤ ta → tb ≤ t.e → ta < tb →
    c.rnd ta = ta → c.rnd tb = tb →
    Refines t t' ∧ WF c t' ∧ find t' ta tb = some ps
  | 0, _, _, _, _, _, _, h, _, _, _, _, _, _ => by simp [locDown] at h
  | fuel + 1, t, ta, tb, t', ps, d, h, hwf, hs, he, hlt, hra, hrb => by
      unfold locDown at h
      simp only [hc.eq, Bool.and_eq_true, decide_eq_true_eq] at h
      split at h
      · rename_i hm
        simp only [Option.some.injEq, Prod.mk.injEq] at h
        obtain ⟨rfl, rfl, _⟩ := h
        refine ⟨Refines.refl _, hwf, ?_⟩
        cases t <;> simp only [Tree.s, Tree.e] at hm <;> simp [find, hm]
      · rename_i hm
        cases t with
        | leaf s e =>
          simp only [Tree.s, Tree.e] at hs he hm
          simp only at h
          split at h
          · simp at h
          · rename_i t1 d1 hsplit
            split at h
            · simp at h
            · rename_i t2 ps2 d2 hrec
              simp only [Option.some.injEq, Prod.mk.injEq] at h
              obtain ⟨rfl, rfl, _⟩ := h
              -- the split point is strictly inside
              have hwf' : s < e := hwf
              by_cases hta : ta = s
              · subst hta
                have htbe : tb ≠ e := fun h' => hm ⟨rfl, h'⟩
                have hx := split_spec hc fuel ta e tb hrb (by simpa using hsplit)
                subst hx
                have hwf1 : WF c (Tree.node ta e tb (Tree.leaf ta tb) (Tree.leaf tb e)) :=
                  ⟨hlt, lt_of_le_of_ne he htbe, hrb, rfl, rfl, rfl, rfl, hlt, lt_of_le_of_ne he htbe⟩
                obtain ⟨r1, w1, f1⟩ := locDown_spec hc fuel _ ta tb hrec hwf1 (le_refl _) he hlt hra hrb
                exact ⟨⟨r1.bounds.1, r1.bounds.2⟩, w1, f1⟩
              · have hsa : s < ta := lt_of_le_of_ne hs (Ne.symm hta)
                have hx := split_spec hc fuel s e ta hra (by simpa [hta] using hsplit)
                subst hx
                have hae : ta < e := lt_of_lt_of_le hlt he
                have hwf1 : WF c (Tree.node s e ta (Tree.leaf s ta) (Tree.leaf ta e)) :=
                  ⟨hsa, hae, hra, rfl, rfl, rfl, rfl, hsa, hae⟩
                obtain ⟨r1, w1, f1⟩ := locDown_spec hc fuel _ ta tb hrec hwf1 hs he hlt hra hrb
                exact ⟨⟨r1.bounds.1, r1.bounds.2⟩, w1, f1⟩
        | node s e m l r =>
          simp only [Tree.s, Tree.e] at hs he hm
          obtain ⟨hsm, hme, hrm, hls, hle, hrs, hre, hwl, hwr⟩ := hwf
          simp only [le, hc.lt, Bool.not_eq_true', decide_eq_false_iff_not, not_lt] at h
          split at h
          · rename_i h1
            split at h
            · simp at h
            · rename_i l' psl dl hrec
              simp only [Option.some.injEq, Prod.mk.injEq] at h
              obtain ⟨rfl, rfl, _⟩ := h
              obtain ⟨r1, w1, f1⟩ := locDown_spec hc fuel l ta tb hrec hwl (hls ▸ hs) (hle ▸ h1) hlt hra hrb
              refine ⟨⟨rfl, rfl, rfl, r1, Refines.refl r⟩,
                ⟨hsm, hme, hrm, r1.bounds.1.trans hls, r1.bounds.2.trans hle, hrs, hre, w1, hwr⟩, ?_⟩
              simp [find, hm, h1, f1]
          · rename_i h1
            split at h
            · rename_i h2
              split at h
              · simp at h
              · rename_i r' psr dr hrec
                simp only [Option.some.injEq, Prod.mk.injEq] at h
                obtain ⟨rfl, rfl, _⟩ := h
                obtain ⟨r1, w1, f1⟩ := locDown_spec hc fuel r ta tb hrec hwr (hrs ▸ h2) (hre ▸ he) hlt hra hrb
                refine ⟨⟨rfl, rfl, rfl, Refines.refl l, r1⟩,
                  ⟨hsm, hme, hrm, hls, hle, r1.bounds.1.trans hrs, r1.bounds.2.trans hre, hwl, w1⟩, ?_⟩
                simp [find, hm, h1, h2, f1]
            · rename_i h2
              split at h
              · simp at h
              · rename_i l' ps1 d1 hrec1
                split at h
                · simp at h
                · rename_i r' ps2 d2 hrec2
                  simp only [Option.some.injEq, Prod.mk.injEq] at h
                  obtain ⟨rfl, rfl, _⟩ := h
                  have hm1 : ta < m := not_le.mp h2
                  have hm2 : m < tb := not_le.mp h1
                  obtain ⟨ra, wa, fa⟩ := locDown_spec hc fuel l ta m hrec1 hwl (hls ▸ hs) (le_of_eq hle.symm) hm1 hra hrm
                  obtain ⟨rb, wb, fb⟩ := locDown_spec hc fuel r m tb hrec2 hwr (le_of_eq hrs) (hre ▸ he) hm2 hrm hrb
                  refine ⟨⟨rfl, rfl, rfl, ra, rb⟩,
                    ⟨hsm, hme, hrm, ra.bounds.1.trans hls, ra.bounds.2.trans hle, rb.bounds.1.trans hrs,
                      rb.bounds.2.trans hre, wa, wb⟩, ?_⟩
                  simp [find, hm, h1, h2, fa, fb]

/-! ### paths -/

@[simp] theorem set_nil (t n : Tree T) : t.set [] n = n := by cases t <;> rfl

theorem get_bounds : ∀ {t : Tree T} {q : Path} {sub : Tree T}, WF c t → t.get? q = some sub →
    t.s ≤ sub.s ∧ sub.e ≤ t.e ∧ WF c sub
  | t, [], sub, hwf, h => by
      simp only [Tree.get?, Option.some.injEq] at h; subst h; exact ⟨le_refl _, le_refl _, hwf⟩
  | Tree.leaf _ _, _ :: _, _, _, h => by simp [Tree.get?] at h
  | Tree.node s e m l r, b :: q, sub, hwf, h => by
      obtain ⟨hsm, hme, _, hls, hle, hrs, hre, hwl, hwr⟩ := hwf
      simp only [Tree.get?] at h
      split at h
      · obtain ⟨h1, h2, h3⟩ := get_bounds hwr h
        exact ⟨le_trans (le_of_lt hsm) (hrs ▸ h1), hre ▸ h2, h3⟩
      · obtain ⟨h1, h2, h3⟩ := get_bounds hwl h
        exact ⟨hls ▸ h1, le_trans h2 (le_of_lt (hle.symm ▸ hme)), h3⟩

theorem get_set : ∀ (t : Tree T) (q : Path) (sub n : Tree T), t.get? q = some sub → (t.set q n).get? q = some n
  | _, [], _, _, _ => by simp [Tree.get?]
  | Tree.leaf _ _, _ :: _, _, _, h => by simp [Tree.get?] at h
  | Tree.node s e m l r, b :: q, sub, n, h => by
      simp only [Tree.get?] at h
      cases b
      · simp only [Bool.false_eq_true, if_false] at h
        simp only [Tree.set, Bool.false_eq_true, if_false, Tree.get?]
        exact get_set l q sub n h
      · simp only [if_true] at h
        simp only [Tree.set, if_true, Tree.get?]
        exact get_set r q sub n h

theorem set_refines : ∀ (t : Tree T) (q : Path) (sub sub' : Tree T), t.get? q = some sub → Refines sub sub' →
    Refines t (t.set q sub')
  | t, [], sub, sub', h, hr => by
      simp only [Tree.get?, Option.some.injEq] at h; subst h; simpa using hr
  | Tree.leaf _ _, _ :: _, _, _, h, _ => by simp [Tree.get?] at h
  | Tree.node s e m l r, b :: q, sub, sub', h, hr => by
      simp only [Tree.get?] at h
      cases b
      · simp only [Bool.false_eq_true, if_false] at h
        simp only [Tree.set, Bool.false_eq_true, if_false]
        exact ⟨rfl, rfl, rfl, set_refines l q sub sub' h hr, Refines.refl r⟩
      · simp only [if_true] at h
        simp only [Tree.set, if_true]
        exact ⟨rfl, rfl, rfl, Refines.refl l, set_refines r q sub sub' h hr⟩

theorem set_wf : ∀ (t : Tree T) (q : Path) (sub sub' : Tree T), WF c t → t.get? q = some sub → WF c sub' →
    sub'.s = sub.s → sub'.e = sub.e → WF c (t.set q sub') ∧ (t.set q sub').s = t.s ∧ (t.set q sub').e = t.e
  | t, [], sub, sub', _, h, hw, hs, he => by
      simp only [Tree.get?, Option.some.injEq] at h; subst h; simpa using ⟨hw, hs, he⟩
  | Tree.leaf _ _, _ :: _, _, _, _, h, _, _, _ => by simp [Tree.get?] at h
  | Tree.node s e m l r, b :: q, sub, sub', hwf, h, hw, hs, he => by
      obtain ⟨hsm, hme, hrm, hls, hle, hrs, hre, hwl, hwr⟩ := hwf
      simp only [Tree.get?] at h
      cases b
      · simp only [Bool.false_eq_true, if_false] at h
        simp only [Tree.set, Bool.false_eq_true, if_false]
        obtain ⟨w, b1, b2⟩ := set_wf l q sub sub' hwl h hw hs he
        exact ⟨⟨hsm, hme, hrm, b1.trans hls, b2.trans hle, hrs, hre, w, hwr⟩, rfl, rfl⟩
      · simp only [if_true] at h
        simp only [Tree.set, if_true]
        obtain ⟨w, b1, b2⟩ := set_wf r q sub sub' hwr h hw hs he
        exact ⟨⟨hsm, hme, hrm, hls, hle, b1.trans hrs, b2.trans hre, hwl, w⟩, rfl, rfl⟩

/-- **The search start is irrelevant.** Searching from the root and searching from any node that has jurisdiction
over the query find the same pieces. -/
theorem find_prefix : ∀ {t : Tree T} {q : Path} {sub : Tree T} {ta tb : T}, WF c t → t.get? q = some sub →
    sub.s ≤ ta → tb ≤ sub.e → ta < tb → find t ta tb = (find sub ta tb).map (·.map (q ++ ·))
  | t, [], sub, ta, tb, _, h, _, _, _ => by
      simp only [Tree.get?, Option.some.injEq] at h; subst h
      cases find t ta tb <;> simp
  | Tree.leaf _ _, _ :: _, _, _, _, _, h, _, _, _ => by simp [Tree.get?] at h
  | Tree.node s e m l r, b :: q, sub, ta, tb, hwf, h, hs, he, hlt => by
      obtain ⟨hsm, hme, hrm, hls, hle, hrs, hre, hwl, hwr⟩ := hwf
      simp only [Tree.get?] at h
      cases b
      · simp only [Bool.false_eq_true, if_false] at h
        obtain ⟨b1, b2, _⟩ := get_bounds hwl h
        have htm : tb ≤ m := le_trans he (hle ▸ b2)
        have hne : ¬ (ta = s ∧ tb = e) := fun hh => absurd (hh.2 ▸ htm) (not_le.mpr hme)
        rw [find, if_neg hne, if_pos htm, find_prefix hwl h hs he hlt]
        cases find sub ta tb <;> simp [List.map_map, Function.comp_def]
      · simp only [if_true] at h
        obtain ⟨b1, b2, _⟩ := get_bounds hwr h
        have hmt : m ≤ ta := le_trans (hrs ▸ b1) hs
        have hne : ¬ (ta = s ∧ tb = e) := fun hh => absurd (hh.1 ▸ hmt) (not_le.mpr hsm)
        have hn2 : ¬ tb ≤ m := not_le.mpr (lt_of_le_of_lt hmt hlt)
        rw [find, if_neg hne, if_neg hn2, if_pos hmt, find_prefix hwr h hs he hlt]
        cases find sub ta tb <;> simp [List.map_map, Function.comp_def]

theorem locUp_spec (hc : Sound c) : ∀ (fuel : Nat) (t : Tree T) (p : Path) (ta tb : T),
    locUp c fuel t p ta tb = [] ∨ jurisdiction c t (locUp c fuel t p ta tb) ta tb = true
  | 0, _, _, _, _ => Or.inl rfl
  | fuel + 1, t, p, ta, tb => by
      unfold locUp
      split
      · rename_i h
        simp only [Bool.or_eq_true] at h
        rcases h with h | h
        · left; simpa using h
        · right; exact h
      · exact locUp_spec hc fuel t p.dropLast ta tb

/-- **`loc` = refine, then find.**  Whatever node the search starts from, the located pieces are exactly what the
split-free search finds in the resulting tree, and the resulting tree refines the old one. -/
theorem loc_spec (hc : Sound c) {fuel : Nat} {t : Tree T} {start : Path} {ta tb : T} {t' ps d}
    (h : loc c fuel t start ta tb = some (t', ps, d)) (hwf : WF c t)
    (hs : t.s ≤ c.rnd ta) (he : c.rnd tb ≤ t.e) (hlt : c.rnd ta < c.rnd tb) :
    Refines t t' ∧ WF c t' ∧ t'.s = t.s ∧ t'.e = t.e ∧ find t' (c.rnd ta) (c.rnd tb) = some ps := by
  unfold loc at h
  simp only at h
  split at h
  · simp at h
  · rename_i sub hget
    split at h
    · simp at h
    · rename_i sub' ps0 d0 hdown
      simp only [Option.some.injEq, Prod.mk.injEq] at h
      obtain ⟨rfl, rfl, _⟩ := h
      obtain ⟨b1, b2, wsub⟩ := get_bounds hwf hget
      -- jurisdiction of the start node found by `locUp`
      have hj : sub.s ≤ c.rnd ta ∧ c.rnd tb ≤ sub.e := by
        rcases locUp_spec hc (start.length + 1) t start (c.rnd ta) (c.rnd tb) with h0 | hj
        · rw [h0] at hget
          simp only [Tree.get?, Option.some.injEq] at hget
          subst hget; exact ⟨hs, he⟩
        · unfold jurisdiction at hj
          rw [hget] at hj
          simp only [hc.lt, Bool.and_eq_true, Bool.not_eq_true', decide_eq_false_iff_not, not_lt] at hj
          exact hj
      obtain ⟨r1, w1, f1⟩ := locDown_spec hc fuel sub _ _ hdown wsub hj.1 hj.2 hlt (hc.rnd_idem _) (hc.rnd_idem _)
      obtain ⟨w2, e1, e2⟩ := set_wf t _ sub sub' hwf hget w1 r1.bounds.1 r1.bounds.2
      refine ⟨set_refines t _ sub sub' hget r1, w2, e1, e2, ?_⟩
      have hg := get_set t _ sub sub' hget
      rw [find_prefix w2 hg (r1.bounds.1 ▸ hj.1) (r1.bounds.2 ▸ hj.2) hlt, f1]
      rfl

/-- **Located pieces are stable.**  Once `[ta, tb]` has been located, locating it again — after ANY further refinement
of the tree and from ANY search start — returns the same list of nodes. -/
theorem loc_stable (hc : Sound c) {fuel fuel' : Nat} {t t1 t2 t3 : Tree T} {start start' : Path} {ta tb : T} {ps ps' d d'}
    (h1 : loc c fuel t start ta tb = some (t1, ps, d)) (hwf : WF c t)
    (hs : t.s ≤ c.rnd ta) (he : c.rnd tb ≤ t.e) (hlt : c.rnd ta < c.rnd tb)
    (href : Refines t1 t2) (hwf2 : WF c t2)
    (h2 : loc c fuel' t2 start' ta tb = some (t3, ps', d')) : ps' = ps := by
  obtain ⟨_, _, e1, e2, f1⟩ := loc_spec hc h1 hwf hs he hlt
  have b2 := href.bounds
  obtain ⟨r3, _, _, _, f3⟩ := loc_spec hc h2 hwf2 (by rw [b2.1, e1]; exact hs) (by rw [b2.2, e2]; exact he) hlt
  have := find_refines f1 (href.trans r3)
  rw [f3] at this
  exact Option.some.inj this

end BMCore
