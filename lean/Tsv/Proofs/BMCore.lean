/-
Core lemmas about the Brownian tree model (`Model/Brownian.lean`): well-formedness, refinement, and the fact that the
search `loc` returns exactly what the split-free search `find` returns on the final tree — from which stability of the
located pieces under later refinement and from any search start follows.  Shared by C03, C05, C06, C07.

Times form an arbitrary linear order, `c.lt`/`c.eq` are its `<`/`=`, `rnd` is an arbitrary idempotent map; values are
completely abstract.  Both tree modes: for `halfway_tree=True` the only extra assumption is `Sound.mid_inside` (the
rounded mid point of an interval that contains a resolved time strictly inside lies strictly inside: true of the decimal
grid `round(x, ndigits)`, where such an interval is at least two grid steps long).
-/
import Tsv.Model.Brownian
import Mathlib.Order.Defs.LinearOrder
import Mathlib.Order.Basic
import Mathlib.Data.List.Basic
import Mathlib.Tactic.Common

namespace BMCore
open Model.BM

variable {T : Type} [LinearOrder T]

/-- the configuration's comparisons are the order's -/
structure Sound (c : Cfg T) : Prop where
  lt : ∀ a b, c.lt a b = decide (a < b)
  eq : ∀ a b, c.eq a b = decide (a = b)
  rnd_idem : ∀ x, c.rnd (c.rnd x) = c.rnd x
  rnd_mono : ∀ a b, a ≤ b → c.rnd a ≤ c.rnd b
  mid_inside : c.halfway = true → ∀ s e x, s < x → x < e → c.rnd x = x →
    s < c.rnd (c.half s e) ∧ c.rnd (c.half s e) < e

/-- children partition the parent, strictly; every mid point is a resolved (rounded) time -/
def WF (c : Cfg T) : Tree T → Prop
  | Tree.leaf s e => s < e ∧ c.rnd s = s ∧ c.rnd e = e
  | Tree.node s e m l r => s < m ∧ m < e ∧ c.rnd m = m ∧ l.s = s ∧ l.e = m ∧ r.s = m ∧ r.e = e ∧ WF c l ∧ WF c r

/-- `t'` is `t` with some leaves replaced by subtrees over the same interval -/
def Refines : Tree T → Tree T → Prop
  | Tree.leaf s e, t' => t'.s = s ∧ t'.e = e
  | Tree.node s e m l r, Tree.node s' e' m' l' r' => s' = s ∧ e' = e ∧ m' = m ∧ Refines l l' ∧ Refines r r'
  | Tree.node _ _ _ _ _, Tree.leaf _ _ => False

theorem Refines.refl : ∀ t : Tree T, Refines t t
  | Tree.leaf _ _ => ⟨rfl, rfl⟩
  | Tree.node _ _ _ l r => ⟨rfl, rfl, rfl, Refines.refl l, Refines.refl r⟩

theorem Refines.bounds : ∀ {t t' : Tree T}, Refines t t' → t'.s = t.s ∧ t'.e = t.e
  | Tree.leaf _ _, _, h => h
  | Tree.node _ _ _ _ _, Tree.node _ _ _ _ _, h => ⟨h.1, h.2.1⟩
  | Tree.node _ _ _ _ _, Tree.leaf _ _, h => h.elim

theorem Refines.trans : ∀ {a b c : Tree T}, Refines a b → Refines b c → Refines a c
  | Tree.leaf _ _, _, _, h1, h2 => ⟨h2.bounds.1.trans h1.1, h2.bounds.2.trans h1.2⟩
  | Tree.node _ _ _ _ _, Tree.node _ _ _ _ _, Tree.node _ _ _ _ _, h1, h2 =>
      ⟨h2.1.trans h1.1, h2.2.1.trans h1.2.1, h2.2.2.1.trans h1.2.2.1, h1.2.2.2.1.trans h2.2.2.2.1,
        h1.2.2.2.2.trans h2.2.2.2.2⟩
  | Tree.node _ _ _ _ _, Tree.node _ _ _ _ _, Tree.leaf _ _, _, h2 => h2.elim
  | Tree.node _ _ _ _ _, Tree.leaf _ _, _, h1, _ => h1.elim

/-- the split-free search: the nodes of `t` that tile `[ta, tb]` the way `_loc_inner` walks -/
def find : Tree T → T → T → Option (List Path)
  | Tree.leaf s e, ta, tb => if ta = s ∧ tb = e then some [[]] else none
  | Tree.node s e m l r, ta, tb =>
    if ta = s ∧ tb = e then some [[]]
    else if tb ≤ m then (find l ta tb).map (·.map (false :: ·))
    else if m ≤ ta then (find r ta tb).map (·.map (true :: ·))
    else
      match find l ta m, find r m tb with
      | some a, some b => some (a.map (false :: ·) ++ b.map (true :: ·))
      | _, _ => none

/-- pieces found once are found again, unchanged, in every refinement of the tree -/
theorem find_refines : ∀ {t t' : Tree T} {ta tb : T} {ps}, find t ta tb = some ps → Refines t t' →
    find t' ta tb = some ps
  | Tree.leaf s e, t', ta, tb, ps, h, hr => by
      simp only [find] at h
      split at h
      · rename_i hm
        cases t' with
        | leaf s' e' => simp only [find]; obtain ⟨h1, h2⟩ := hr; simp only [Tree.s, Tree.e] at h1 h2; simp [h1, h2, hm, h]
        | node s' e' m' l' r' =>
            simp only [find]; obtain ⟨h1, h2⟩ := hr; simp only [Tree.s, Tree.e] at h1 h2; simp [h1, h2, hm, h]
      · simp at h
  | Tree.node s e m l r, Tree.leaf _ _, _, _, _, _, hr => hr.elim
  | Tree.node s e m l r, Tree.node s' e' m' l' r', ta, tb, ps, h, hr => by
      obtain ⟨rfl, rfl, rfl, hl, hrr⟩ := hr
      simp only [find] at h ⊢
      split
      · rename_i hm; simpa [hm] using h
      · rename_i hm
        simp only [hm, if_false] at h
        split
        · rename_i h1
          simp only [h1, if_true] at h
          cases hf : find l ta tb with
          | none => simp [hf] at h
          | some a => rw [find_refines hf hl]; simpa [hf] using h
        · rename_i h1
          simp only [h1, if_false] at h
          split
          · rename_i h2
            simp only [h2, if_true] at h
            cases hf : find r ta tb with
            | none => simp [hf] at h
            | some a => rw [find_refines hf hrr]; simpa [hf] using h
          · rename_i h2
            simp only [h2, if_false] at h
            split at h
            · rename_i a b hf1 hf2
              rw [find_refines hf1 hl, find_refines hf2 hrr]
              simpa using h
            · simp at h

/-! ### `locDown` -/

variable {c : Cfg T}

theorem splitHalf_wf (hc : Sound c) (hh : c.halfway = true) : ∀ (fuel : Nat) (s e x : T) {t' d},
    splitHalf c fuel s e x = some (t', d) → s < x → x < e → c.rnd x = x → c.rnd s = s → c.rnd e = e →
    WF c t' ∧ t'.s = s ∧ t'.e = e
  | 0, _, _, _, _, _, h, _, _, _, _, _ => by simp [splitHalf] at h
  | fuel + 1, s, e, x, t', d, h, h1, h2, hx, hs, he => by
      obtain ⟨m1, m2⟩ := hc.mid_inside hh s e x h1 h2 hx
      have hm := hc.rnd_idem (c.half s e)
      simp only [splitHalf, hc.lt, decide_eq_true_eq] at h
      split at h
      · rename_i hlt
        split at h
        · simp at h
        · rename_i r dr hr
          simp only [Option.some.injEq, Prod.mk.injEq] at h
          obtain ⟨rfl, _⟩ := h
          obtain ⟨w, b1, b2⟩ := splitHalf_wf hc hh fuel _ e x hr hlt h2 hx hm he
          exact ⟨⟨m1, m2, hm, rfl, rfl, b1, b2, ⟨m1, hs, hm⟩, w⟩, rfl, rfl⟩
      · split at h
        · rename_i hgt
          split at h
          · simp at h
          · rename_i l dl hl
            simp only [Option.some.injEq, Prod.mk.injEq] at h
            obtain ⟨rfl, _⟩ := h
            obtain ⟨w, b1, b2⟩ := splitHalf_wf hc hh fuel s _ x hl h1 hgt hx hs hm
            exact ⟨⟨m1, m2, hm, b1, b2, rfl, rfl, w, ⟨m2, hm, he⟩⟩, rfl, rfl⟩
        · simp only [Option.some.injEq, Prod.mk.injEq] at h
          obtain ⟨rfl, _⟩ := h
          exact ⟨⟨m1, m2, hm, rfl, rfl, rfl, rfl, ⟨m1, hs, hm⟩, ⟨m2, hm, he⟩⟩, rfl, rfl⟩

/-- `_split(x)` of a leaf at a resolved time strictly inside it gives a well-formed subtree over the same interval -/
theorem split_wf (hc : Sound c) (fuel : Nat) (s e x : T) {t' d} (h : split c fuel s e x = some (t', d))
    (h1 : s < x) (h2 : x < e) (hx : c.rnd x = x) (hs : c.rnd s = s) (he : c.rnd e = e) :
    WF c t' ∧ t'.s = s ∧ t'.e = e := by
  unfold split at h
  split at h
  · rename_i hh; exact splitHalf_wf hc hh fuel s e x h h1 h2 hx hs he
  · simp only [Option.some.injEq, Prod.mk.injEq] at h
    obtain ⟨rfl, _⟩ := h
    simp only [splitExact, hx]
    exact ⟨⟨h1, h2, hx, rfl, rfl, rfl, rfl, ⟨h1, hs, hx⟩, ⟨h2, hx, he⟩⟩, rfl, rfl⟩

/-- `locDown` only refines, keeps strict well-formedness, and returns what `find` finds afterwards -/
theorem locDown_spec (hc : Sound c) : ∀ (fuel : Nat) (t : Tree T) (ta tb : T) {t' ps d},
    locDown c fuel t ta tb = some (t', ps, d) → WF c t → t.s ≤ ta → tb ≤ t.e → ta < tb →
    c.rnd ta = ta → c.rnd tb = tb →
    Refines t t' ∧ WF c t' ∧ find t' ta tb = some ps
  | 0, _, _, _, _, _, _, h, _, _, _, _, _, _ => by simp [locDown] at h
  | fuel + 1, t, ta, tb, t', ps, d, h, hwf, hs, he, hlt, hra, hrb => by
      unfold locDown at h
      simp only [hc.eq, Bool.and_eq_true, decide_eq_true_eq] at h
      split at h
      · rename_i hm
        simp only [Option.some.injEq, Prod.mk.injEq] at h
        obtain ⟨rfl, rfl, _⟩ := h
        refine ⟨Refines.refl _, hwf, ?_⟩
        cases t <;> simp only [Tree.s, Tree.e] at hm <;> simp [find, hm]
      · rename_i hm
        cases t with
        | leaf s e =>
          simp only [Tree.s, Tree.e] at hs he hm
          simp only at h
          split at h
          · simp at h
          · rename_i t1 d1 hsplit
            split at h
            · simp at h
            · rename_i t2 ps2 d2 hrec
              simp only [Option.some.injEq, Prod.mk.injEq] at h
              obtain ⟨rfl, rfl, _⟩ := h
              -- the split point is strictly inside
              obtain ⟨hwf', hrs0, hre0⟩ := hwf
              by_cases hta : ta = s
              · subst hta
                have htbe : tb ≠ e := fun h' => hm ⟨rfl, h'⟩
                obtain ⟨w1, b1, b2⟩ := split_wf hc fuel ta e tb (by simpa using hsplit) hlt (lt_of_le_of_ne he htbe)
                  hrb hrs0 hre0
                obtain ⟨r1, w2, f1⟩ := locDown_spec hc fuel _ ta tb hrec w1 (le_of_eq b1) (b2 ▸ he) hlt hra hrb
                exact ⟨⟨r1.bounds.1.trans b1, r1.bounds.2.trans b2⟩, w2, f1⟩
              · have hsa : s < ta := lt_of_le_of_ne hs (Ne.symm hta)
                have hae : ta < e := lt_of_lt_of_le hlt he
                obtain ⟨w1, b1, b2⟩ := split_wf hc fuel s e ta (by simpa [hta] using hsplit) hsa hae hra hrs0 hre0
                obtain ⟨r1, w2, f1⟩ := locDown_spec hc fuel _ ta tb hrec w1 (b1 ▸ hs) (b2 ▸ he) hlt hra hrb
                exact ⟨⟨r1.bounds.1.trans b1, r1.bounds.2.trans b2⟩, w2, f1⟩
        | node s e m l r =>
          simp only [Tree.s, Tree.e] at hs he hm
          obtain ⟨hsm, hme, hrm, hls, hle, hrs, hre, hwl, hwr⟩ := hwf
          simp only [le, hc.lt, Bool.not_eq_true', decide_eq_false_iff_not, not_lt] at h
          split at h
          · rename_i h1
            split at h
            · simp at h
            · rename_i l' psl dl hrec
              simp only [Option.some.injEq, Prod.mk.injEq] at h
              obtain ⟨rfl, rfl, _⟩ := h
              obtain ⟨r1, w1, f1⟩ := locDown_spec hc fuel l ta tb hrec hwl (hls ▸ hs) (hle ▸ h1) hlt hra hrb
              refine ⟨⟨rfl, rfl, rfl, r1, Refines.refl r⟩,
                ⟨hsm, hme, hrm, r1.bounds.1.trans hls, r1.bounds.2.trans hle, hrs, hre, w1, hwr⟩, ?_⟩
              simp [find, hm, h1, f1]
          · rename_i h1
            split at h
            · rename_i h2
              split at h
              · simp at h
              · rename_i r' psr dr hrec
                simp only [Option.some.injEq, Prod.mk.injEq] at h
                obtain ⟨rfl, rfl, _⟩ := h
                obtain ⟨r1, w1, f1⟩ := locDown_spec hc fuel r ta tb hrec hwr (hrs ▸ h2) (hre ▸ he) hlt hra hrb
                refine ⟨⟨rfl, rfl, rfl, Refines.refl l, r1⟩,
                  ⟨hsm, hme, hrm, hls, hle, r1.bounds.1.trans hrs, r1.bounds.2.trans hre, hwl, w1⟩, ?_⟩
                simp [find, hm, h1, h2, f1]
            · rename_i h2
              split at h
              · simp at h
              · rename_i l' ps1 d1 hrec1
                split at h
                · simp at h
                · rename_i r' ps2 d2 hrec2
                  simp only [Option.some.injEq, Prod.mk.injEq] at h
                  obtain ⟨rfl, rfl, _⟩ := h
                  have hm1 : ta < m := not_le.mp h2
                  have hm2 : m < tb := not_le.mp h1
                  obtain ⟨ra, wa, fa⟩ := locDown_spec hc fuel l ta m hrec1 hwl (hls ▸ hs) (le_of_eq hle.symm) hm1 hra hrm
                  obtain ⟨rb, wb, fb⟩ := locDown_spec hc fuel r m tb hrec2 hwr (le_of_eq hrs) (hre ▸ he) hm2 hrm hrb
                  refine ⟨⟨rfl, rfl, rfl, ra, rb⟩,
                    ⟨hsm, hme, hrm, ra.bounds.1.trans hls, ra.bounds.2.trans hle, rb.bounds.1.trans hrs,
                      rb.bounds.2.trans hre, wa, wb⟩, ?_⟩
                  simp [find, hm, h1, h2, fa, fb]

/-- node bounds are resolved times -/
theorem wf_rnd : ∀ {t : Tree T}, WF c t → c.rnd t.s = t.s ∧ c.rnd t.e = t.e ∧ t.s < t.e
  | Tree.leaf _ _, h => ⟨h.2.1, h.2.2, h.1⟩
  | Tree.node _ _ _ l r, h => by
      obtain ⟨hsm, hme, _, hls, _, _, hre, hwl, hwr⟩ := h
      exact ⟨hls ▸ (wf_rnd hwl).1, hre ▸ (wf_rnd hwr).2.1, lt_trans hsm hme⟩

/-! ### paths -/

@[simp] theorem set_nil (t n : Tree T) : t.set [] n = n := by cases t <;> rfl

theorem get_bounds : ∀ {t : Tree T} {q : Path} {sub : Tree T}, WF c t → t.get? q = some sub →
    t.s ≤ sub.s ∧ sub.e ≤ t.e ∧ WF c sub
  | t, [], sub, hwf, h => by
      simp only [Tree.get?, Option.some.injEq] at h; subst h; exact ⟨le_refl _, le_refl _, hwf⟩
  | Tree.leaf _ _, _ :: _, _, _, h => by simp [Tree.get?] at h
  | Tree.node s e m l r, b :: q, sub, hwf, h => by
      obtain ⟨hsm, hme, _, hls, hle, hrs, hre, hwl, hwr⟩ := hwf
      simp only [Tree.get?] at h
      split at h
      · obtain ⟨h1, h2, h3⟩ := get_bounds hwr h
        exact ⟨le_trans (le_of_lt hsm) (hrs ▸ h1), hre ▸ h2, h3⟩
      · obtain ⟨h1, h2, h3⟩ := get_bounds hwl h
        exact ⟨hls ▸ h1, le_trans h2 (le_of_lt (hle.symm ▸ hme)), h3⟩

theorem get_set : ∀ (t : Tree T) (q : Path) (sub n : Tree T), t.get? q = some sub → (t.set q n).get? q = some n
  | _, [], _, _, _ => by simp [Tree.get?]
  | Tree.leaf _ _, _ :: _, _, _, h => by simp [Tree.get?] at h
  | Tree.node s e m l r, b :: q, sub, n, h => by
      simp only [Tree.get?] at h
      cases b
      · simp only [Bool.false_eq_true, if_false] at h
        simp only [Tree.set, Bool.false_eq_true, if_false, Tree.get?]
        exact get_set l q sub n h
      · simp only [if_true] at h
        simp only [Tree.set, if_true, Tree.get?]
        exact get_set r q sub n h

theorem set_refines : ∀ (t : Tree T) (q : Path) (sub sub' : Tree T), t.get? q = some sub → Refines sub sub' →
    Refines t (t.set q sub')
  | t, [], sub, sub', h, hr => by
      simp only [Tree.get?, Option.some.injEq] at h; subst h; simpa using hr
  | Tree.leaf _ _, _ :: _, _, _, h, _ => by simp [Tree.get?] at h
  | Tree.node s e m l r, b :: q, sub, sub', h, hr => by
      simp only [Tree.get?] at h
      cases b
      · simp only [Bool.false_eq_true, if_false] at h
        simp only [Tree.set, Bool.false_eq_true, if_false]
        exact ⟨rfl, rfl, rfl, set_refines l q sub sub' h hr, Refines.refl r⟩
      · simp only [if_true] at h
        simp only [Tree.set, if_true]
        exact ⟨rfl, rfl, rfl, Refines.refl l, set_refines r q sub sub' h hr⟩

theorem set_wf : ∀ (t : Tree T) (q : Path) (sub sub' : Tree T), WF c t → t.get? q = some sub → WF c sub' →
    sub'.s = sub.s → sub'.e = sub.e → WF c (t.set q sub') ∧ (t.set q sub').s = t.s ∧ (t.set q sub').e = t.e
  | t, [], sub, sub', _, h, hw, hs, he => by
      simp only [Tree.get?, Option.some.injEq] at h; subst h; simpa using ⟨hw, hs, he⟩
  | Tree.leaf _ _, _ :: _, _, _, _, h, _, _, _ => by simp [Tree.get?] at h
  | Tree.node s e m l r, b :: q, sub, sub', hwf, h, hw, hs, he => by
      obtain ⟨hsm, hme, hrm, hls, hle, hrs, hre, hwl, hwr⟩ := hwf
      simp only [Tree.get?] at h
      cases b
      · simp only [Bool.false_eq_true, if_false] at h
        simp only [Tree.set, Bool.false_eq_true, if_false]
        obtain ⟨w, b1, b2⟩ := set_wf l q sub sub' hwl h hw hs he
        exact ⟨⟨hsm, hme, hrm, b1.trans hls, b2.trans hle, hrs, hre, w, hwr⟩, rfl, rfl⟩
      · simp only [if_true] at h
        simp only [Tree.set, if_true]
        obtain ⟨w, b1, b2⟩ := set_wf r q sub sub' hwr h hw hs he
        exact ⟨⟨hsm, hme, hrm, hls, hle, b1.trans hrs, b2.trans hre, hwl, w⟩, rfl, rfl⟩

/-- **The search start is irrelevant.** Searching from the root and searching from any node that has jurisdiction
over the query find the same pieces. -/
theorem find_prefix : ∀ {t : Tree T} {q : Path} {sub : Tree T} {ta tb : T}, WF c t → t.get? q = some sub →
    sub.s ≤ ta → tb ≤ sub.e → ta < tb → find t ta tb = (find sub ta tb).map (·.map (q ++ ·))
  | t, [], sub, ta, tb, _, h, _, _, _ => by
      simp only [Tree.get?, Option.some.injEq] at h; subst h
      cases find t ta tb <;> simp
  | Tree.leaf _ _, _ :: _, _, _, _, _, h, _, _, _ => by simp [Tree.get?] at h
  | Tree.node s e m l r, b :: q, sub, ta, tb, hwf, h, hs, he, hlt => by
      obtain ⟨hsm, hme, hrm, hls, hle, hrs, hre, hwl, hwr⟩ := hwf
      simp only [Tree.get?] at h
      cases b
      · simp only [Bool.false_eq_true, if_false] at h
        obtain ⟨b1, b2, _⟩ := get_bounds hwl h
        have htm : tb ≤ m := le_trans he (hle ▸ b2)
        have hne : ¬ (ta = s ∧ tb = e) := fun hh => absurd (hh.2 ▸ htm) (not_le.mpr hme)
        rw [find, if_neg hne, if_pos htm, find_prefix hwl h hs he hlt]
        cases find sub ta tb <;> simp [List.map_map, Function.comp_def]
      · simp only [if_true] at h
        obtain ⟨b1, b2, _⟩ := get_bounds hwr h
        have hmt : m ≤ ta := le_trans (hrs ▸ b1) hs
        have hne : ¬ (ta = s ∧ tb = e) := fun hh => absurd (hh.1 ▸ hmt) (not_le.mpr hsm)
        have hn2 : ¬ tb ≤ m := not_le.mpr (lt_of_le_of_lt hmt hlt)
        rw [find, if_neg hne, if_neg hn2, if_pos hmt, find_prefix hwr h hs he hlt]
        cases find sub ta tb <;> simp [List.map_map, Function.comp_def]

theorem locUp_spec (hc : Sound c) : ∀ (fuel : Nat) (t : Tree T) (p : Path) (ta tb : T),
    locUp c fuel t p ta tb = [] ∨ jurisdiction c t (locUp c fuel t p ta tb) ta tb = true
  | 0, _, _, _, _ => Or.inl rfl
  | fuel + 1, t, p, ta, tb => by
      unfold locUp
      split
      · rename_i h
        simp only [Bool.or_eq_true] at h
        rcases h with h | h
        · left; simpa using h
        · right; exact h
      · exact locUp_spec hc fuel t p.dropLast ta tb

/-- **`loc` = refine, then find.**  Whatever node the search starts from, the located pieces are exactly what the
split-free search finds in the resulting tree, and the resulting tree refines the old one. -/
theorem loc_spec (hc : Sound c) {fuel : Nat} {t : Tree T} {start : Path} {ta tb : T} {t' ps d}
    (h : loc c fuel t start ta tb = some (t', ps, d)) (hwf : WF c t)
    (hs : t.s ≤ c.rnd ta) (he : c.rnd tb ≤ t.e) (hlt : c.rnd ta < c.rnd tb) :
    Refines t t' ∧ WF c t' ∧ t'.s = t.s ∧ t'.e = t.e ∧ find t' (c.rnd ta) (c.rnd tb) = some ps := by
  unfold loc at h
  simp only at h
  split at h
  · simp at h
  · rename_i sub hget
    split at h
    · simp at h
    · rename_i sub' ps0 d0 hdown
      simp only [Option.some.injEq, Prod.mk.injEq] at h
      obtain ⟨rfl, rfl, _⟩ := h
      obtain ⟨b1, b2, wsub⟩ := get_bounds hwf hget
      -- jurisdiction of the start node found by `locUp`
      have hj : sub.s ≤ c.rnd ta ∧ c.rnd tb ≤ sub.e := by
        rcases locUp_spec hc (start.length + 1) t start (c.rnd ta) (c.rnd tb) with h0 | hj
        · rw [h0] at hget
          simp only [Tree.get?, Option.some.injEq] at hget
          subst hget; exact ⟨hs, he⟩
        · unfold jurisdiction at hj
          rw [hget] at hj
          simp only [hc.lt, Bool.and_eq_true, Bool.not_eq_true', decide_eq_false_iff_not, not_lt] at hj
          exact hj
      obtain ⟨r1, w1, f1⟩ := locDown_spec hc fuel sub _ _ hdown wsub hj.1 hj.2 hlt (hc.rnd_idem _) (hc.rnd_idem _)
      obtain ⟨w2, e1, e2⟩ := set_wf t _ sub sub' hwf hget w1 r1.bounds.1 r1.bounds.2
      refine ⟨set_refines t _ sub sub' hget r1, w2, e1, e2, ?_⟩
      have hg := get_set t _ sub sub' hget
      rw [find_prefix w2 hg (r1.bounds.1 ▸ hj.1) (r1.bounds.2 ▸ hj.2) hlt, f1]
      rfl

/-- **Located pieces are stable.**  Once `[ta, tb]` has been located, locating it again — after ANY further refinement
of the tree and from ANY search start — returns the same list of nodes. -/
theorem loc_stable (hc : Sound c) {fuel fuel' : Nat} {t t1 t2 t3 : Tree T} {start start' : Path} {ta tb : T} {ps ps' d d'}
    (h1 : loc c fuel t start ta tb = some (t1, ps, d)) (hwf : WF c t)
    (hs : t.s ≤ c.rnd ta) (he : c.rnd tb ≤ t.e) (hlt : c.rnd ta < c.rnd tb)
    (href : Refines t1 t2) (hwf2 : WF c t2)
    (h2 : loc c fuel' t2 start' ta tb = some (t3, ps', d')) : ps' = ps := by
  obtain ⟨_, _, e1, e2, f1⟩ := loc_spec hc h1 hwf hs he hlt
  have b2 := href.bounds
  obtain ⟨r3, _, _, _, f3⟩ := loc_spec hc h2 hwf2 (by rw [b2.1, e1]; exact hs) (by rw [b2.2, e2]; exact he) hlt
  have := find_refines f1 (href.trans r3)
  rw [f3] at this
  exact Option.some.inj this

end BMCore
