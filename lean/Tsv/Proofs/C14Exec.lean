/-
C14 — the EXECUTABLE adaptive loop (`Model.Loop.aadvance`, the fuelled function the correspondence driver runs against the real
`integrate`) and the relational semantics `C14.AReaches` (what the C14 / C14Term theorems are about) describe the same runs.

`aadvance_reaches`: whatever the fuelled loop returns is a run of `AReaches` (so `accepted_tile`, `accepted_end`, `trial_ge_dtmin`, …
apply to every result the driver ever printed); `areaches_aadvance`: every run of `AReaches` is returned by the fuelled loop for some
fuel (so with `C14Term.adaptive_terminates` the executable model returns for some fuel, whatever the error oracle).
Times form an arbitrary linear order; `add`, `half`, `err`, `update` are arbitrary functions.
-/
import Tsv.Proofs.C14Term

namespace C14Exec
open Model.Loop LoopCore C14
set_option linter.unusedSectionVars false

variable {T Y X : Type} [LinearOrder T]
variable {tEnd : T} {step : T → T → Y → X → Y × X}
variable {add : T → T → T} {half : T → T → T} {err : Y → Y → T} {update : T → T → Option T → Ctl T} {dtMin one : T}

local notation "AITER" => aiter tEnd step add half err update dtMin one
local notation "REACH" => AReaches tEnd step add half err update dtMin one
local notation "AADV" => aadvance tEnd step add half err update dtMin one

/-- soundness of the executable loop w.r.t. the relational semantics -/
theorem aadvance_reaches : ∀ (fuel : Nat) (out : T) (a : ASt T Y X) (log : List (T × T)) (tr : List (Trial T)) {a' log' tr'},
    AADV fuel out a log tr = some (a', log', tr') → ∃ acc, REACH out a a' acc
  | 0, _, _, _, _, _, _, _, h => by simp [aadvance] at h
  | fuel + 1, out, a, log, tr, a', log', tr', h => by
      unfold aadvance at h
      split at h
      · rename_i hlt
        obtain ⟨acc, hr⟩ := aadvance_reaches fuel out _ _ _ h
        cases hacc : (AITER a).2.1 with
        | false => exact ⟨acc, AReaches.rej hlt hacc hr⟩
        | true => exact ⟨_, AReaches.acc hlt hacc hr⟩
      · rename_i hnl
        simp only [Option.some.injEq, Prod.mk.injEq] at h
        obtain ⟨rfl, _, _⟩ := h
        exact ⟨[], AReaches.stop hnl⟩

/-- completeness: every relational run is computed by the executable loop for some fuel -/
theorem areaches_aadvance {out : T} {a a' : ASt T Y X} {acc} (h : REACH out a a' acc) :
    ∃ fuel, ∀ log tr, ∃ log' tr', AADV fuel out a log tr = some (a', log', tr') := by
  induction h with
  | stop hnl => exact ⟨1, fun log tr => ⟨log, tr, by simp [aadvance, hnl]⟩⟩
  | rej hlt _ _ ih =>
      obtain ⟨fuel, hf⟩ := ih
      refine ⟨fuel + 1, fun log tr => ?_⟩
      unfold aadvance
      rw [if_pos hlt]
      exact hf _ _
  | acc hlt _ _ ih =>
      obtain ⟨fuel, hf⟩ := ih
      refine ⟨fuel + 1, fun log tr => ?_⟩
      unfold aadvance
      rw [if_pos hlt]
      exact hf _ _

/-- the final state of the executable loop is unique (independent of the fuel that sufficed) -/
theorem aadvance_exit {fuel : Nat} {out : T} {a a' : ASt T Y X} {log tr log' tr'}
    (h : AADV fuel out a log tr = some (a', log', tr')) : ¬ a'.s.ct < out := by
  induction fuel generalizing a log tr with
  | zero => simp [aadvance] at h
  | succ fuel ih =>
      unfold aadvance at h
      split at h
      · exact ih h
      · rename_i hnl
        simp only [Option.some.injEq, Prod.mk.injEq] at h
        obtain ⟨rfl, _, _⟩ := h
        exact hnl

/-! ### the executable adaptive loop returns -/
section defined
variable {K : Type} [Field K] [LinearOrder K] [IsStrictOrderedRing K] [Archimedean K]
variable {tEnd : K} {step : K → K → Y → X → Y × X}
variable {half : K → K → K} {err : Y → Y → K} {update : K → K → Option K → Ctl K} {dtMin one c : K}

/-- For every error oracle, a contracting controller and `dt_min > 0`, the fuelled adaptive loop that the correspondence driver runs
returns a result for some fuel (and that result satisfies every `AReaches` theorem by `aadvance_reaches`): running out of fuel is
a matter of the driver's constant, never of the loop. -/
theorem aadvance_defined (hpos : 0 < dtMin) (hc0 : 0 ≤ c) (hc1 : c < 1)
    (hc : ∀ e h p, one < e → (update e h p).h ≤ c * h) (out : K) (hout : out ≤ tEnd) (a : ASt K Y X) (ha : dtMin ≤ a.h) :
    ∃ fuel a', ∀ log tr, ∃ log' tr',
      aadvance tEnd step (fun x y : K => x + y) half err update dtMin one fuel out a log tr = some (a', log', tr') := by
  obtain ⟨a', acc, hr⟩ := C14Term.adaptive_terminates (step := step) (half := half) (err := err) hpos hc0 hc1 hc out hout a ha
  obtain ⟨fuel, hf⟩ := areaches_aadvance hr
  exact ⟨fuel, a', hf⟩

end defined

end C14Exec
