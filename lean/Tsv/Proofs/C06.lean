/-
C06 — seeded reproducibility; query-order independence in dyadic-tree mode.

(a) "Same entropy, same options, same query sequence ⇒ same results": in the model `call` is a FUNCTION of
    (configuration, state, query) and the initial state is a function of (options, entropy) — there is no hidden input.
    What this needs from the code (the global RNG is consulted only when `entropy is None`) is checked on the real objects.
(b) With `halfway_tree=True` every tree the object can reach is a pruning of ONE infinite dyadic tree: every mid point is
    `round(½(start+end))`.  Hence the located pieces and their values — so the answer — depend only on the query, not on
    the history: `order_independent` below, for two ARBITRARY histories (different query sets, not just permutations).
    Values are abstract (no arithmetic law): bit-identical.
(c) "different entropies give different paths" is a statement about numpy's SeedSequence: not provable, sampled on the real code.
-/
import Tsv.Proofs.C05

namespace C06
open Model.BM BMCore C05

variable {T V : Type} [LinearOrder T] {c : Cfg T} (o : Ops T V) (a : Arith T)

/-- every mid point is the rounded half-way point -/
def Dyadic (c : Cfg T) : Tree T → Prop
  | Tree.leaf _ _ => True
  | Tree.node s e m l r => m = c.rnd (c.half s e) ∧ Dyadic c l ∧ Dyadic c r

theorem splitHalf_dyadic : ∀ (fuel : Nat) (s e x : T) {t' d}, splitHalf c fuel s e x = some (t', d) → Dyadic c t'
  | 0, _, _, _, _, _, h => by simp [splitHalf] at h
  | fuel + 1, s, e, x, t', d, h => by
      simp only [splitHalf] at h
      split at h
      · split at h
        · simp at h
        · rename_i r dr hr
          simp only [Option.some.injEq, Prod.mk.injEq] at h
          obtain ⟨rfl, _⟩ := h
          exact ⟨rfl, trivial, splitHalf_dyadic fuel _ e x hr⟩
      · split at h
        · split at h
          · simp at h
          · rename_i l dl hl
            simp only [Option.some.injEq, Prod.mk.injEq] at h
            obtain ⟨rfl, _⟩ := h
            exact ⟨rfl, splitHalf_dyadic fuel s _ x hl, trivial⟩
        · simp only [Option.some.injEq, Prod.mk.injEq] at h
          obtain ⟨rfl, _⟩ := h
          exact ⟨rfl, trivial, trivial⟩

theorem locDown_dyadic (hh : c.halfway = true) : ∀ (fuel : Nat) (t : Tree T) (ta tb : T) {t' ps d},
    locDown c fuel t ta tb = some (t', ps, d) → Dyadic c t → Dyadic c t'
  | 0, _, _, _, _, _, _, h, _ => by simp [locDown] at h
  | fuel + 1, t, ta, tb, t', ps, d, h, hd => by
      unfold locDown at h
      split at h
      · simp only [Option.some.injEq, Prod.mk.injEq] at h
        obtain ⟨rfl, _⟩ := h; exact hd
      · cases t with
        | leaf s e =>
          simp only at h
          split at h
          · simp at h
          · rename_i t1 d1 hsplit
            split at h
            · simp at h
            · rename_i t2 ps2 d2 hrec
              simp only [Option.some.injEq, Prod.mk.injEq] at h
              obtain ⟨rfl, _⟩ := h
              have : Dyadic c t1 := by
                unfold split at hsplit
                simp only [hh, if_true] at hsplit
                exact splitHalf_dyadic fuel s e _ hsplit
              exact locDown_dyadic hh fuel t1 ta tb hrec this
        | node s e m l r =>
          obtain ⟨hm, hl, hr⟩ := hd
          simp only at h
          split at h
          · split at h
            · simp at h
            · rename_i l' _ _ hrec
              simp only [Option.some.injEq, Prod.mk.injEq] at h
              obtain ⟨rfl, _⟩ := h
              exact ⟨hm, locDown_dyadic hh fuel l ta tb hrec hl, hr⟩
          · split at h
            · split at h
              · simp at h
              · rename_i r' _ _ hrec
                simp only [Option.some.injEq, Prod.mk.injEq] at h
                obtain ⟨rfl, _⟩ := h
                exact ⟨hm, hl, locDown_dyadic hh fuel r ta tb hrec hr⟩
            · split at h
              · simp at h
              · rename_i l' _ _ hrec1
                split at h
                · simp at h
                · rename_i r' _ _ hrec2
                  simp only [Option.some.injEq, Prod.mk.injEq] at h
                  obtain ⟨rfl, _⟩ := h
                  exact ⟨hm, locDown_dyadic hh fuel l ta m hrec1 hl, locDown_dyadic hh fuel r m tb hrec2 hr⟩

theorem get_dyadic : ∀ {t : Tree T} {q : Path} {sub : Tree T}, Dyadic c t → t.get? q = some sub → Dyadic c sub
  | t, [], sub, hd, h => by simp only [Tree.get?, Option.some.injEq] at h; subst h; exact hd
  | Tree.leaf _ _, _ :: _, _, _, h => by simp [Tree.get?] at h
  | Tree.node _ _ _ l r, b :: q, sub, hd, h => by
      simp only [Tree.get?] at h
      cases b
      · exact get_dyadic hd.2.1 (by simpa using h)
      · exact get_dyadic hd.2.2 (by simpa using h)

theorem set_dyadic : ∀ (t : Tree T) (q : Path) (n : Tree T), Dyadic c t → Dyadic c n → Dyadic c (t.set q n)
  | t, [], n, _, hn => by simpa using hn
  | Tree.leaf _ _, _ :: _, _, hd, _ => by simpa [Tree.set] using hd
  | Tree.node s e m l r, b :: q, n, hd, hn => by
      cases b
      · simp only [Tree.set, Bool.false_eq_true, if_false]
        exact ⟨hd.1, set_dyadic l q n hd.2.1 hn, hd.2.2⟩
      · simp only [Tree.set, if_true]
        exact ⟨hd.1, hd.2.1, set_dyadic r q n hd.2.2 hn⟩

theorem loc_dyadic (hh : c.halfway = true) {fuel : Nat} {t : Tree T} {start : Path} {ta tb : T} {t' ps d}
    (h : loc c fuel t start ta tb = some (t', ps, d)) (hd : Dyadic c t) : Dyadic c t' := by
  unfold loc at h
  simp only at h
  split at h
  · simp at h
  · rename_i sub hget
    split at h
    · simp at h
    · rename_i sub' ps0 d0 hdown
      simp only [Option.some.injEq, Prod.mk.injEq] at h
      obtain ⟨rfl, _⟩ := h
      exact set_dyadic t _ sub' hd (locDown_dyadic hh fuel sub _ _ hdown (get_dyadic hd hget))

/-! ### two dyadic trees over the same interval agree wherever both are defined -/

theorem find_dyadic_unique : ∀ {t1 t2 : Tree T} {ta tb : T} {p1 p2 : List Path}, WF c t1 → WF c t2 → Dyadic c t1 →
    Dyadic c t2 → t1.s = t2.s → t1.e = t2.e → find t1 ta tb = some p1 → find t2 ta tb = some p2 → p1 = p2
  | Tree.leaf s e, t2, ta, tb, p1, p2, _, _, _, _, hs, he, f1, f2 => by
      simp only [find] at f1
      split at f1
      · rename_i hm
        simp only [Tree.s, Tree.e] at hs he
        cases t2 <;> simp only [find, Tree.s, Tree.e] at f2 hs he <;> simp [← hs, ← he, hm] at f2 <;>
          simp only [Option.some.injEq] at f1 <;> rw [← f1, ← f2]
      · simp at f1
  | Tree.node s e m l r, Tree.leaf s' e', ta, tb, p1, p2, _, _, _, _, hs, he, f1, f2 => by
      simp only [find] at f2
      split at f2
      · rename_i hm
        simp only [Tree.s, Tree.e] at hs he
        simp only [find, hs, he, hm, and_self, if_true, Option.some.injEq] at f1
        simp only [Option.some.injEq] at f2
        rw [← f1, ← f2]
      · simp at f2
  | Tree.node s e m l r, Tree.node s' e' m' l' r', ta, tb, p1, p2, w1, w2, d1, d2, hs, he, f1, f2 => by
      simp only [Tree.s, Tree.e] at hs he
      subst hs he
      have hm : m' = m := by rw [d1.1, d2.1]
      subst hm
      obtain ⟨_, _, _, ls, le, rs, re, wl, wr⟩ := w1
      obtain ⟨_, _, _, ls', le', rs', re', wl', wr'⟩ := w2
      simp only [find] at f1 f2
      split at f1
      · rename_i hmatch
        simp only [hmatch, and_self, if_true, Option.some.injEq] at f2
        simp only [Option.some.injEq] at f1
        rw [← f1, ← f2]
      · rename_i hmatch
        simp only [hmatch, if_false] at f2
        split at f1
        · rename_i h1
          simp only [h1, if_true] at f2
          cases hf1 : find l ta tb with
          | none => simp [hf1] at f1
          | some a1 =>
            cases hf2 : find l' ta tb with
            | none => simp [hf2] at f2
            | some a2 =>
              have := find_dyadic_unique wl wl' d1.2.1 d2.2.1 (ls.trans ls'.symm) (le.trans le'.symm) hf1 hf2
              subst this
              simp only [hf1, Option.map_some, Option.some.injEq] at f1
              simp only [hf2, Option.map_some, Option.some.injEq] at f2
              rw [← f1, ← f2]
        · rename_i h1
          simp only [h1, if_false] at f2
          split at f1
          · rename_i h2
            simp only [h2, if_true] at f2
            cases hf1 : find r ta tb with
            | none => simp [hf1] at f1
            | some a1 =>
              cases hf2 : find r' ta tb with
              | none => simp [hf2] at f2
              | some a2 =>
                have := find_dyadic_unique wr wr' d1.2.2 d2.2.2 (rs.trans rs'.symm) (re.trans re'.symm) hf1 hf2
                subst this
                simp only [hf1, Option.map_some, Option.some.injEq] at f1
                simp only [hf2, Option.map_some, Option.some.injEq] at f2
                rw [← f1, ← f2]
          · rename_i h2
            simp only [h2, if_false] at f2
            split at f1
            · rename_i a1 b1 hfa hfb
              split at f2
              · rename_i a2 b2 hfa' hfb'
                have e1 := find_dyadic_unique wl wl' d1.2.1 d2.2.1 (ls.trans ls'.symm) (le.trans le'.symm) hfa hfa'
                have e2 := find_dyadic_unique wr wr' d1.2.2 d2.2.2 (rs.trans rs'.symm) (re.trans re'.symm) hfb hfb'
                subst e1 e2
                simp only [Option.some.injEq] at f1 f2
                rw [← f1, ← f2]
              · simp at f2
            · simp at f1

/-- values and node bounds along a path agree in two dyadic trees over the same interval -/
theorem valueAt_dyadic : ∀ {t1 t2 : Tree T} {p pre : Path} {top v1 v2 : V × V}, WF c t1 → WF c t2 → Dyadic c t1 →
    Dyadic c t2 → t1.s = t2.s → t1.e = t2.e → valueAt o top t1 p pre = some v1 → valueAt o top t2 p pre = some v2 →
    v1 = v2
  | t1, t2, [], pre, top, v1, v2, _, _, _, _, _, _, h1, h2 => by
      rw [valueAt_nil] at h1 h2; exact (Option.some.inj h1).symm.trans (Option.some.inj h2)
  | Tree.leaf _ _, _, _ :: _, _, _, _, _, _, _, _, _, _, _, h1, _ => by simp [valueAt] at h1
  | Tree.node _ _ _ _ _, Tree.leaf _ _, _ :: _, _, _, _, _, _, _, _, _, _, _, _, h2 => by simp [valueAt] at h2
  | Tree.node s e m l r, Tree.node s' e' m' l' r', b :: p, pre, top, v1, v2, w1, w2, d1, d2, hs, he, h1, h2 => by
      simp only [Tree.s, Tree.e] at hs he
      subst hs he
      have hm : m' = m := by rw [d1.1, d2.1]
      subst hm
      obtain ⟨_, _, _, ls, le, rs, re, wl, wr⟩ := w1
      obtain ⟨_, _, _, ls', le', rs', re', wl', wr'⟩ := w2
      simp only [valueAt] at h1 h2
      cases b
      · exact valueAt_dyadic wl wl' d1.2.1 d2.2.1 (ls.trans ls'.symm) (le.trans le'.symm) h1 h2
      · exact valueAt_dyadic wr wr' d1.2.2 d2.2.2 (rs.trans rs'.symm) (re.trans re'.symm) h1 h2

theorem get_dyadic_bounds : ∀ {t1 t2 : Tree T} {p : Path} {n1 n2 : Tree T}, WF c t1 → WF c t2 → Dyadic c t1 →
    Dyadic c t2 → t1.s = t2.s → t1.e = t2.e → t1.get? p = some n1 → t2.get? p = some n2 → n1.s = n2.s ∧ n1.e = n2.e
  | t1, t2, [], n1, n2, _, _, _, _, hs, he, h1, h2 => by
      simp only [Tree.get?, Option.some.injEq] at h1 h2; subst h1 h2; exact ⟨hs, he⟩
  | Tree.leaf _ _, _, _ :: _, _, _, _, _, _, _, _, _, h1, _ => by simp [Tree.get?] at h1
  | Tree.node _ _ _ _ _, Tree.leaf _ _, _ :: _, _, _, _, _, _, _, _, _, _, h2 => by simp [Tree.get?] at h2
  | Tree.node s e m l r, Tree.node s' e' m' l' r', b :: p, n1, n2, w1, w2, d1, d2, hs, he, h1, h2 => by
      simp only [Tree.s, Tree.e] at hs he
      subst hs he
      obtain ⟨_, _, _, ls, le, rs, re, wl, wr⟩ := w1
      obtain ⟨_, _, _, ls', le', rs', re', wl', wr'⟩ := w2
      have hm : m' = m := by rw [d1.1, d2.1]
      subst hm
      simp only [Tree.get?] at h1 h2
      cases b
      · exact get_dyadic_bounds wl wl' d1.2.1 d2.2.1 (ls.trans ls'.symm) (le.trans le'.symm) (by simpa using h1) (by simpa using h2)
      · exact get_dyadic_bounds wr wr' d1.2.2 d2.2.2 (rs.trans rs'.symm) (re.trans re'.symm) (by simpa using h1) (by simpa using h2)

theorem foldSpec_dyadic {t1 t2 : Tree T} {top : V × V} {ta : T} (w1 : WF c t1) (w2 : WF c t2) (d1 : Dyadic c t1)
    (d2 : Dyadic c t2) (hs : t1.s = t2.s) (he : t1.e = t2.e) :
    ∀ {ps : List Path} {acc r1 r2 : V × V}, foldSpec o t1 top ta acc ps = some r1 →
      foldSpec o t2 top ta acc ps = some r2 → r1 = r2
  | [], acc, r1, r2, h1, h2 => by
      simp only [foldSpec, Option.some.injEq] at h1 h2; rw [← h1, ← h2]
  | p :: more, acc, r1, r2, h1, h2 => by
      simp only [foldSpec] at h1 h2
      split at h1
      · rename_i v1 n1 hv1 hg1
        split at h2
        · rename_i v2 n2 hv2 hg2
          have ev := valueAt_dyadic o w1 w2 d1 d2 hs he hv1 hv2
          obtain ⟨b1, b2⟩ := get_dyadic_bounds w1 w2 d1 d2 hs he hg1 hg2
          subst ev
          rw [b1, b2] at h1
          exact foldSpec_dyadic w1 w2 d1 d2 hs he h1 h2
        · simp at h2
      · simp at h1

/-! ### the object in dyadic mode -/

/-- invariant of a `halfway_tree=True` object -/
structure GoodD (st : State T V) : Prop extends Good (c := c) o st where
  dy : Dyadic c st.tree

theorem call_dyadic (hc : Sound c) (hh : c.halfway = true) {fuel : Nat} {st st' : State T V} {ta tb : T} {ans : Ans V}
    (hg : GoodD (c := c) o st) (h1 : st.tree.s ≤ ta) (h2 : ta ≤ tb) (h3 : tb ≤ st.tree.e)
    (h : call c o a fuel st ta tb = some (st', ans)) : Dyadic c st'.tree := by
  unfold call at h
  have c1 : c.lt ta st.tree.s = false := by rw [hc.lt]; simpa using h1
  have c2 : c.lt tb st.tree.s = false := by rw [hc.lt]; simpa using le_trans h1 h2
  have c3 : c.lt st.tree.e ta = false := by rw [hc.lt]; simpa using le_trans h2 h3
  have c4 : c.lt st.tree.e tb = false := by rw [hc.lt]; simpa using h3
  have c5 : c.lt tb ta = false := by rw [hc.lt]; simpa using h2
  simp only [c1, c2, c3, c4, c5, Bool.false_eq_true, if_false, statsPhase, hh, Bool.not_true, Bool.and_false] at h
  split at h
  · simp only [Option.some.injEq, Prod.mk.injEq] at h
    obtain ⟨rfl, _⟩ := h; exact hg.dy
  · split at h
    · simp at h
    · rename_i tree' ps sd hloc
      split at h
      · simp at h
      · split at h
        · simp at h
        · split at h
          · simp at h
          · simp only [Option.some.injEq, Prod.mk.injEq] at h
            obtain ⟨rfl, _⟩ := h
            exact loc_dyadic hh hloc hg.dy

/-- any sequence of in-range queries on a dyadic object keeps it dyadic -/
theorem reach_dyadic (hc : Sound c) (hh : c.halfway = true) {st st' : State T V} (h : Reach (c := c) o a st st')
    (hg : GoodD (c := c) o st) : GoodD (c := c) o st' ∧ st'.top = st.top ∧ st'.tree.s = st.tree.s ∧
      st'.tree.e = st.tree.e := by
  induction h with
  | refl st => exact ⟨hg, rfl, rfl, rfl⟩
  | step h1 h2 h3 hcall _ ih =>
      obtain ⟨g1, _, t1, e1, e2, _⟩ := call_spec o a hc hg.toGood h1 h2 h3 hcall
      have d1 := call_dyadic o a hc hh hg h1 h2 h3 hcall
      obtain ⟨g2, t2, e3, e4⟩ := ih ⟨g1, d1⟩
      exact ⟨g2, t2.trans t1, e3.trans e1, e4.trans e2⟩

/-- **C06 (dyadic mode).**  Two objects built alike (`st0`), driven through two ARBITRARY, unrelated query histories,
return the same `W` and `U` for any query they are then both asked. -/
theorem order_independent (hc : Sound c) (hh : c.halfway = true) {fuel fuel' : Nat} {st0 sA sB sA' sB' : State T V}
    {ta tb : T} {aA aB : Ans V} (hg : GoodD (c := c) o st0)
    (histA : Reach (c := c) o a st0 sA) (histB : Reach (c := c) o a st0 sB)
    (h1 : st0.tree.s ≤ ta) (h2 : ta ≤ tb) (h3 : tb ≤ st0.tree.e)
    (qA : call c o a fuel sA ta tb = some (sA', aA)) (qB : call c o a fuel' sB ta tb = some (sB', aB)) :
    aA.W = aB.W ∧ aA.U = aB.U := by
  obtain ⟨gA, tA, sA1, sA2⟩ := reach_dyadic o a hc hh histA hg
  obtain ⟨gB, tB, sB1, sB2⟩ := reach_dyadic o a hc hh histB hg
  have hA1 : sA.tree.s ≤ ta := by rw [sA1]; exact h1
  have hA3 : tb ≤ sA.tree.e := by rw [sA2]; exact h3
  have hB1 : sB.tree.s ≤ ta := by rw [sB1]; exact h1
  have hB3 : tb ≤ sB.tree.e := by rw [sB2]; exact h3
  obtain ⟨gA', _, _, eA1, eA2, ansA⟩ := call_spec o a hc gA.toGood hA1 h2 hA3 qA
  obtain ⟨gB', _, _, eB1, eB2, ansB⟩ := call_spec o a hc gB.toGood hB1 h2 hB3 qB
  have dA := call_dyadic o a hc hh gA hA1 h2 hA3 qA
  have dB := call_dyadic o a hc hh gB hB1 h2 hB3 qB
  have hs : sA'.tree.s = sB'.tree.s := by rw [eA1, eB1, sA1, sB1]
  have he : sA'.tree.e = sB'.tree.e := by rw [eA2, eB2, sA2, sB2]
  rcases ansA with ⟨hz, w1, u1⟩ | ⟨hlt, ps1, f1, s1⟩
  · rcases ansB with ⟨_, w2, u2⟩ | ⟨hlt2, _⟩
    · exact ⟨w1.trans w2.symm, u1.trans u2.symm⟩
    · exact absurd hz (ne_of_lt hlt2)
  · rcases ansB with ⟨hz2, _⟩ | ⟨_, ps2, f2, s2⟩
    · exact absurd hz2 (ne_of_lt hlt)
    · have hps := find_dyadic_unique gA'.wf gB'.wf dA dB hs he f1 f2
      subst hps
      rw [tA] at s1
      rw [tB] at s2
      cases ps1 with
      | nil => simp [answerSpec] at s1
      | cons p0 rest =>
        simp only [answerSpec] at s1 s2
        split at s1
        · simp at s1
        · rename_i v1 hv1
          split at s2
          · simp at s2
          · rename_i v2 hv2
            have ev := valueAt_dyadic o gA'.wf gB'.wf dA dB hs he hv1 hv2
            subst ev
            split at s1
            · simp at s1
            · rename_i wh1 hf1
              split at s2
              · simp at s2
              · rename_i wh2 hf2
                have ew := foldSpec_dyadic o gA'.wf gB'.wf dA dB hs he hf1 hf2
                subst ew
                have := (Option.some.inj s1).symm.trans (Option.some.inj s2)
                exact ⟨congrArg Prod.fst this, congrArg Prod.snd this⟩

end C06
