/-
C02 — each solver step matches the stochastic Taylor expansion of the declared SDE (scalar SDE, generic jets).

WRITTEN BY vlib/author_c02.py from the traced steps; COMMITTED; re-checked on every run against the definitions that are
regenerated from /repo (lean/Tsv/Gen/Steps.lean).  For every solver x noise type at d = m = 1:

  step(t0, t0 + s², y0, ΔW = sξ, U = s³ζ)  =  y0 + s·T1 + … + s^n·Tn  +  s^(n+1)·M(ξ,ζ)  +  s^(n+2)·R        (n = 2·strong order)

for the polynomial SDE with GENERIC jets `Fij`, `Gij` (one graded order more than can influence grade n+1), `Tk` the
hand-written Itô–Taylor terms of Spec/Taylor.lean, `M` the explicit grade-(n+1) coefficient, `R` an explicit polynomial —
so every term of mean-square size below h^(p+1/2) agrees IDENTICALLY — and `E[M] = E[Taylor grade n+1]` — the expectation
agrees to O(h^(p+1)).  Proof: unfold the regenerated step, `field_simp`, `ring`.
-/
import Tsv.Gen.Steps
import Tsv.Spec.Taylor
import Mathlib.Tactic.Ring
import Mathlib.Tactic.FieldSimp
import Mathlib.Algebra.CharZero.Defs

namespace C02T
open Spec.Taylor
set_option linter.unusedSectionVars false
set_option linter.unusedVariables false
set_option linter.unusedSimpArgs false
variable {K : Type} [Field K] [LinearOrder K] [CharZero K]


/-- `euler_heun_s_additive_11`: grade-3 coefficient of the step, as a polynomial in (ξ, ζ) -/
def euler_heun_s_additive_11_Mc (F00 F01 F02 F10 G00 G10 : K) : Nat → Nat → K
  | 1, 0 => (1/2) * G10
  | _, _ => 0
def euler_heun_s_additive_11_supp : List (Nat × Nat) := [(1, 0)]

/-- `euler_heun_s_additive_11` (advertised strong order 1.0): the step agrees with the Stratonovich (as Itô with drift f + ½ g g_y)–Taylor expansion in every grade ≤ 2;
    the remainder beyond grade 3 is an explicit polynomial. -/
theorem euler_heun_s_additive_11_taylor (F00 F01 F02 F10 G00 G10 t0 y0 s ξ : K) :
    Gen.euler_heun_s_additive_11_y1_0_0 (fun t y => F00 + F01 * (y - y0) + F02 * (y - y0)^2 + F10 * (t - t0)) (fun t => G00 + G10 * (t - t0)) t0 (t0 + s^2) y0 (s * ξ)
      = y0 + s * T1 G00 ξ + s^2 * T2 F00 G00 0 ξ + s^3 * polyXZ (euler_heun_s_additive_11_Mc F00 F01 F02 F10 G00 G10) euler_heun_s_additive_11_supp ξ 0
        + s^4 * (0) := by
  simp only [Gen.euler_heun_s_additive_11_y1_0_0, T1, T2, T3, strat_a00, strat_a01, polyXZ, euler_heun_s_additive_11_Mc, euler_heun_s_additive_11_supp, List.map, List.sum_cons, List.sum_nil, add_sub_cancel_left]
  try (first | (field_simp; ring) | ring)

/-- `euler_heun_s_additive_11`: the mean of the grade-3 coefficient equals the mean of the Taylor expansion's (so the local mean error is O(h^2.0)) -/
theorem euler_heun_s_additive_11_mean (F00 F01 F02 F10 G00 G10 : K) :
    gaussE (euler_heun_s_additive_11_Mc F00 F01 F02 F10 G00 G10) euler_heun_s_additive_11_supp = 0 := by
  simp only [gaussE, euler_heun_s_additive_11_Mc, euler_heun_s_additive_11_supp, List.map, List.sum_cons, List.sum_nil, moment, mean4, strat_a00, strat_a01]
  try (first | (field_simp; ring) | ring)

/-- `euler_heun_s_diagonal_11`: grade-3 coefficient of the step, as a polynomial in (ξ, ζ) -/
def euler_heun_s_diagonal_11_Mc (F00 F01 F02 F10 G00 G01 G02 G03 G10 G11 : K) : Nat → Nat → K
  | 1, 0 => (1/2) * G10
  | 3, 0 => (1/2) * G00^2 * G02
  | _, _ => 0
def euler_heun_s_diagonal_11_supp : List (Nat × Nat) := [(1, 0), (3, 0)]

/-- `euler_heun_s_diagonal_11` (advertised strong order 1.0): the step agrees with the Stratonovich (as Itô with drift f + ½ g g_y)–Taylor expansion in every grade ≤ 2;
    the remainder beyond grade 3 is an explicit polynomial. -/
theorem euler_heun_s_diagonal_11_taylor (F00 F01 F02 F10 G00 G01 G02 G03 G10 G11 t0 y0 s ξ : K) :
    Gen.euler_heun_s_diagonal_11_y1_0_0 (fun t y => F00 + F01 * (y - y0) + F02 * (y - y0)^2 + F10 * (t - t0)) (fun t y => G00 + G01 * (y - y0) + G02 * (y - y0)^2 + G03 * (y - y0)^3 + G10 * (t - t0) + G11 * (t - t0) * (y - y0)) t0 (t0 + s^2) y0 (s * ξ)
      = y0 + s * T1 G00 ξ + s^2 * T2 (strat_a00 F00 G00 G01) G00 G01 ξ + s^3 * polyXZ (euler_heun_s_diagonal_11_Mc F00 F01 F02 F10 G00 G01 G02 G03 G10 G11) euler_heun_s_diagonal_11_supp ξ 0
        + s^4 * ((1/2) * G00 * G11 * ξ^2 + (1/2) * G00^3 * G03 * ξ^4) := by
  simp only [Gen.euler_heun_s_diagonal_11_y1_0_0, T1, T2, T3, strat_a00, strat_a01, polyXZ, euler_heun_s_diagonal_11_Mc, euler_heun_s_diagonal_11_supp, List.map, List.sum_cons, List.sum_nil, add_sub_cancel_left]
  try (first | (field_simp; ring) | ring)

/-- `euler_heun_s_diagonal_11`: the mean of the grade-3 coefficient equals the mean of the Taylor expansion's (so the local mean error is O(h^2.0)) -/
theorem euler_heun_s_diagonal_11_mean (F00 F01 F02 F10 G00 G01 G02 G03 G10 G11 : K) :
    gaussE (euler_heun_s_diagonal_11_Mc F00 F01 F02 F10 G00 G01 G02 G03 G10 G11) euler_heun_s_diagonal_11_supp = 0 := by
  simp only [gaussE, euler_heun_s_diagonal_11_Mc, euler_heun_s_diagonal_11_supp, List.map, List.sum_cons, List.sum_nil, moment, mean4, strat_a00, strat_a01]
  try (first | (field_simp; ring) | ring)

/-- `euler_heun_s_general_11`: grade-2 coefficient of the step, as a polynomial in (ξ, ζ) -/
def euler_heun_s_general_11_Mc (F00 F01 G00 G01 G02 G10 : K) : Nat → Nat → K
  | 0, 0 => F00
  | 2, 0 => (1/2) * G00 * G01
  | _, _ => 0
def euler_heun_s_general_11_supp : List (Nat × Nat) := [(0, 0), (2, 0)]

/-- `euler_heun_s_general_11` (advertised strong order 0.5): the step agrees with the Stratonovich (as Itô with drift f + ½ g g_y)–Taylor expansion in every grade ≤ 1;
    the remainder beyond grade 2 is an explicit polynomial. -/
theorem euler_heun_s_general_11_taylor (F00 F01 G00 G01 G02 G10 t0 y0 s ξ : K) :
    Gen.euler_heun_s_general_11_y1_0_0 (fun t y => F00 + F01 * (y - y0)) (fun t y => G00 + G01 * (y - y0) + G02 * (y - y0)^2 + G10 * (t - t0)) t0 (t0 + s^2) y0 (s * ξ)
      = y0 + s * T1 G00 ξ + s^2 * polyXZ (euler_heun_s_general_11_Mc F00 F01 G00 G01 G02 G10) euler_heun_s_general_11_supp ξ 0
        + s^3 * ((1/2) * G10 * ξ + (1/2) * G00^2 * G02 * ξ^3) := by
  simp only [Gen.euler_heun_s_general_11_y1_0_0, T1, T2, T3, strat_a00, strat_a01, polyXZ, euler_heun_s_general_11_Mc, euler_heun_s_general_11_supp, List.map, List.sum_cons, List.sum_nil, add_sub_cancel_left]
  try (first | (field_simp; ring) | ring)

/-- `euler_heun_s_general_11`: the mean of the grade-2 coefficient equals the mean of the Taylor expansion's (so the local mean error is O(h^1.5)) -/
theorem euler_heun_s_general_11_mean (F00 F01 G00 G01 G02 G10 : K) :
    gaussE (euler_heun_s_general_11_Mc F00 F01 G00 G01 G02 G10) euler_heun_s_general_11_supp = (strat_a00 F00 G00 G01) := by
  simp only [gaussE, euler_heun_s_general_11_Mc, euler_heun_s_general_11_supp, List.map, List.sum_cons, List.sum_nil, moment, mean4, strat_a00, strat_a01]
  try (first | (field_simp; ring) | ring)

/-- `euler_heun_s_scalar_11`: grade-3 coefficient of the step, as a polynomial in (ξ, ζ) -/
def euler_heun_s_scalar_11_Mc (F00 F01 F02 F10 G00 G01 G02 G03 G10 G11 : K) : Nat → Nat → K
  | 1, 0 => (1/2) * G10
  | 3, 0 => (1/2) * G00^2 * G02
  | _, _ => 0
def euler_heun_s_scalar_11_supp : List (Nat × Nat) := [(1, 0), (3, 0)]

/-- `euler_heun_s_scalar_11` (advertised strong order 1.0): the step agrees with the Stratonovich (as Itô with drift f + ½ g g_y)–Taylor expansion in every grade ≤ 2;
    the remainder beyond grade 3 is an explicit polynomial. -/
theorem euler_heun_s_scalar_11_taylor (F00 F01 F02 F10 G00 G01 G02 G03 G10 G11 t0 y0 s ξ : K) :
    Gen.euler_heun_s_scalar_11_y1_0_0 (fun t y => F00 + F01 * (y - y0) + F02 * (y - y0)^2 + F10 * (t - t0)) (fun t y => G00 + G01 * (y - y0) + G02 * (y - y0)^2 + G03 * (y - y0)^3 + G10 * (t - t0) + G11 * (t - t0) * (y - y0)) t0 (t0 + s^2) y0 (s * ξ)
      = y0 + s * T1 G00 ξ + s^2 * T2 (strat_a00 F00 G00 G01) G00 G01 ξ + s^3 * polyXZ (euler_heun_s_scalar_11_Mc F00 F01 F02 F10 G00 G01 G02 G03 G10 G11) euler_heun_s_scalar_11_supp ξ 0
        + s^4 * ((1/2) * G00 * G11 * ξ^2 + (1/2) * G00^3 * G03 * ξ^4) := by
  simp only [Gen.euler_heun_s_scalar_11_y1_0_0, T1, T2, T3, strat_a00, strat_a01, polyXZ, euler_heun_s_scalar_11_Mc, euler_heun_s_scalar_11_supp, List.map, List.sum_cons, List.sum_nil, add_sub_cancel_left]
  try (first | (field_simp; ring) | ring)

/-- `euler_heun_s_scalar_11`: the mean of the grade-3 coefficient equals the mean of the Taylor expansion's (so the local mean error is O(h^2.0)) -/
theorem euler_heun_s_scalar_11_mean (F00 F01 F02 F10 G00 G01 G02 G03 G10 G11 : K) :
    gaussE (euler_heun_s_scalar_11_Mc F00 F01 F02 F10 G00 G01 G02 G03 G10 G11) euler_heun_s_scalar_11_supp = 0 := by
  simp only [gaussE, euler_heun_s_scalar_11_Mc, euler_heun_s_scalar_11_supp, List.map, List.sum_cons, List.sum_nil, moment, mean4, strat_a00, strat_a01]
  try (first | (field_simp; ring) | ring)

/-- `euler_i_additive_11`: grade-3 coefficient of the step, as a polynomial in (ξ, ζ) -/
def euler_i_additive_11_Mc (F00 F01 F02 F10 G00 G10 : K) : Nat → Nat → K
  | _, _ => 0
def euler_i_additive_11_supp : List (Nat × Nat) := []

/-- `euler_i_additive_11` (advertised strong order 1.0): the step agrees with the Itô–Taylor expansion in every grade ≤ 2;
    the remainder beyond grade 3 is an explicit polynomial. -/
theorem euler_i_additive_11_taylor (F00 F01 F02 F10 G00 G10 t0 y0 s ξ : K) :
    Gen.euler_i_additive_11_y1_0_0 (fun t y => F00 + F01 * (y - y0) + F02 * (y - y0)^2 + F10 * (t - t0)) (fun t => G00 + G10 * (t - t0)) t0 (t0 + s^2) y0 (s * ξ)
      = y0 + s * T1 G00 ξ + s^2 * T2 F00 G00 0 ξ + s^3 * polyXZ (euler_i_additive_11_Mc F00 F01 F02 F10 G00 G10) euler_i_additive_11_supp ξ 0
        + s^4 * (0) := by
  simp only [Gen.euler_i_additive_11_y1_0_0, T1, T2, T3, strat_a00, strat_a01, polyXZ, euler_i_additive_11_Mc, euler_i_additive_11_supp, List.map, List.sum_cons, List.sum_nil, add_sub_cancel_left]
  try (first | (field_simp; ring) | ring)

/-- `euler_i_additive_11`: the mean of the grade-3 coefficient equals the mean of the Taylor expansion's (so the local mean error is O(h^2.0)) -/
theorem euler_i_additive_11_mean (F00 F01 F02 F10 G00 G10 : K) :
    gaussE (euler_i_additive_11_Mc F00 F01 F02 F10 G00 G10) euler_i_additive_11_supp = 0 := by
  simp only [gaussE, euler_i_additive_11_Mc, euler_i_additive_11_supp, List.map, List.sum_cons, List.sum_nil, moment, mean4, strat_a00, strat_a01]
  try (first | (field_simp; ring) | ring)

/-- `euler_i_diagonal_11`: grade-2 coefficient of the step, as a polynomial in (ξ, ζ) -/
def euler_i_diagonal_11_Mc (F00 F01 G00 G01 G02 G10 : K) : Nat → Nat → K
  | 0, 0 => F00
  | _, _ => 0
def euler_i_diagonal_11_supp : List (Nat × Nat) := [(0, 0)]

/-- `euler_i_diagonal_11` (advertised strong order 0.5): the step agrees with the Itô–Taylor expansion in every grade ≤ 1;
    the remainder beyond grade 2 is an explicit polynomial. -/
theorem euler_i_diagonal_11_taylor (F00 F01 G00 G01 G02 G10 t0 y0 s ξ : K) :
    Gen.euler_i_diagonal_11_y1_0_0 (fun t y => F00 + F01 * (y - y0)) (fun t y => G00 + G01 * (y - y0) + G02 * (y - y0)^2 + G10 * (t - t0)) t0 (t0 + s^2) y0 (s * ξ)
      = y0 + s * T1 G00 ξ + s^2 * polyXZ (euler_i_diagonal_11_Mc F00 F01 G00 G01 G02 G10) euler_i_diagonal_11_supp ξ 0
        + s^3 * (0) := by
  simp only [Gen.euler_i_diagonal_11_y1_0_0, T1, T2, T3, strat_a00, strat_a01, polyXZ, euler_i_diagonal_11_Mc, euler_i_diagonal_11_supp, List.map, List.sum_cons, List.sum_nil, add_sub_cancel_left]
  try (first | (field_simp; ring) | ring)

/-- `euler_i_diagonal_11`: the mean of the grade-2 coefficient equals the mean of the Taylor expansion's (so the local mean error is O(h^1.5)) -/
theorem euler_i_diagonal_11_mean (F00 F01 G00 G01 G02 G10 : K) :
    gaussE (euler_i_diagonal_11_Mc F00 F01 G00 G01 G02 G10) euler_i_diagonal_11_supp = F00 := by
  simp only [gaussE, euler_i_diagonal_11_Mc, euler_i_diagonal_11_supp, List.map, List.sum_cons, List.sum_nil, moment, mean4, strat_a00, strat_a01]
  try (first | (field_simp; ring) | ring)

/-- `euler_i_general_11`: grade-2 coefficient of the step, as a polynomial in (ξ, ζ) -/
def euler_i_general_11_Mc (F00 F01 G00 G01 G02 G10 : K) : Nat → Nat → K
  | 0, 0 => F00
  | _, _ => 0
def euler_i_general_11_supp : List (Nat × Nat) := [(0, 0)]

/-- `euler_i_general_11` (advertised strong order 0.5): the step agrees with the Itô–Taylor expansion in every grade ≤ 1;
    the remainder beyond grade 2 is an explicit polynomial. -/
theorem euler_i_general_11_taylor (F00 F01 G00 G01 G02 G10 t0 y0 s ξ : K) :
    Gen.euler_i_general_11_y1_0_0 (fun t y => F00 + F01 * (y - y0)) (fun t y => G00 + G01 * (y - y0) + G02 * (y - y0)^2 + G10 * (t - t0)) t0 (t0 + s^2) y0 (s * ξ)
      = y0 + s * T1 G00 ξ + s^2 * polyXZ (euler_i_general_11_Mc F00 F01 G00 G01 G02 G10) euler_i_general_11_supp ξ 0
        + s^3 * (0) := by
  simp only [Gen.euler_i_general_11_y1_0_0, T1, T2, T3, strat_a00, strat_a01, polyXZ, euler_i_general_11_Mc, euler_i_general_11_supp, List.map, List.sum_cons, List.sum_nil, add_sub_cancel_left]
  try (first | (field_simp; ring) | ring)

/-- `euler_i_general_11`: the mean of the grade-2 coefficient equals the mean of the Taylor expansion's (so the local mean error is O(h^1.5)) -/
theorem euler_i_general_11_mean (F00 F01 G00 G01 G02 G10 : K) :
    gaussE (euler_i_general_11_Mc F00 F01 G00 G01 G02 G10) euler_i_general_11_supp = F00 := by
  simp only [gaussE, euler_i_general_11_Mc, euler_i_general_11_supp, List.map, List.sum_cons, List.sum_nil, moment, mean4, strat_a00, strat_a01]
  try (first | (field_simp; ring) | ring)

/-- `euler_i_scalar_11`: grade-2 coefficient of the step, as a polynomial in (ξ, ζ) -/
def euler_i_scalar_11_Mc (F00 F01 G00 G01 G02 G10 : K) : Nat → Nat → K
  | 0, 0 => F00
  | _, _ => 0
def euler_i_scalar_11_supp : List (Nat × Nat) := [(0, 0)]

/-- `euler_i_scalar_11` (advertised strong order 0.5): the step agrees with the Itô–Taylor expansion in every grade ≤ 1;
    the remainder beyond grade 2 is an explicit polynomial. -/
theorem euler_i_scalar_11_taylor (F00 F01 G00 G01 G02 G10 t0 y0 s ξ : K) :
    Gen.euler_i_scalar_11_y1_0_0 (fun t y => F00 + F01 * (y - y0)) (fun t y => G00 + G01 * (y - y0) + G02 * (y - y0)^2 + G10 * (t - t0)) t0 (t0 + s^2) y0 (s * ξ)
      = y0 + s * T1 G00 ξ + s^2 * polyXZ (euler_i_scalar_11_Mc F00 F01 G00 G01 G02 G10) euler_i_scalar_11_supp ξ 0
        + s^3 * (0) := by
  simp only [Gen.euler_i_scalar_11_y1_0_0, T1, T2, T3, strat_a00, strat_a01, polyXZ, euler_i_scalar_11_Mc, euler_i_scalar_11_supp, List.map, List.sum_cons, List.sum_nil, add_sub_cancel_left]
  try (first | (field_simp; ring) | ring)

/-- `euler_i_scalar_11`: the mean of the grade-2 coefficient equals the mean of the Taylor expansion's (so the local mean error is O(h^1.5)) -/
theorem euler_i_scalar_11_mean (F00 F01 G00 G01 G02 G10 : K) :
    gaussE (euler_i_scalar_11_Mc F00 F01 G00 G01 G02 G10) euler_i_scalar_11_supp = F00 := by
  simp only [gaussE, euler_i_scalar_11_Mc, euler_i_scalar_11_supp, List.map, List.sum_cons, List.sum_nil, moment, mean4, strat_a00, strat_a01]
  try (first | (field_simp; ring) | ring)

/-- `heun_s_additive_11`: grade-3 coefficient of the step, as a polynomial in (ξ, ζ) -/
def heun_s_additive_11_Mc (F00 F01 F02 F10 G00 G10 : K) : Nat → Nat → K
  | 1, 0 => (1/2) * G10 + (1/2) * F01 * G00
  | _, _ => 0
def heun_s_additive_11_supp : List (Nat × Nat) := [(1, 0)]

/-- `heun_s_additive_11` (advertised strong order 1.0): the step agrees with the Stratonovich (as Itô with drift f + ½ g g_y)–Taylor expansion in every grade ≤ 2;
    the remainder beyond grade 3 is an explicit polynomial. -/
theorem heun_s_additive_11_taylor (F00 F01 F02 F10 G00 G10 t0 y0 s ξ : K) :
    Gen.heun_s_additive_11_y1_0_0 (fun t y => F00 + F01 * (y - y0) + F02 * (y - y0)^2 + F10 * (t - t0)) (fun t => G00 + G10 * (t - t0)) t0 (t0 + s^2) y0 (s * ξ)
      = y0 + s * T1 G00 ξ + s^2 * T2 F00 G00 0 ξ + s^3 * polyXZ (heun_s_additive_11_Mc F00 F01 F02 F10 G00 G10) heun_s_additive_11_supp ξ 0
        + s^4 * ((1/2) * F10 + (1/2) * F00 * F01 + F00 * F02 * G00 * s * ξ + (1/2) * F00^2 * F02 * s^2 + (1/2) * F02 * G00^2 * ξ^2) := by
  simp only [Gen.heun_s_additive_11_y1_0_0, T1, T2, T3, strat_a00, strat_a01, polyXZ, heun_s_additive_11_Mc, heun_s_additive_11_supp, List.map, List.sum_cons, List.sum_nil, add_sub_cancel_left]
  try (first | (field_simp; ring) | ring)

/-- `heun_s_additive_11`: the mean of the grade-3 coefficient equals the mean of the Taylor expansion's (so the local mean error is O(h^2.0)) -/
theorem heun_s_additive_11_mean (F00 F01 F02 F10 G00 G10 : K) :
    gaussE (heun_s_additive_11_Mc F00 F01 F02 F10 G00 G10) heun_s_additive_11_supp = 0 := by
  simp only [gaussE, heun_s_additive_11_Mc, heun_s_additive_11_supp, List.map, List.sum_cons, List.sum_nil, moment, mean4, strat_a00, strat_a01]
  try (first | (field_simp; ring) | ring)

/-- `heun_s_diagonal_11`: grade-3 coefficient of the step, as a polynomial in (ξ, ζ) -/
def heun_s_diagonal_11_Mc (F00 F01 F02 F10 G00 G01 G02 G03 G10 G11 : K) : Nat → Nat → K
  | 1, 0 => (1/2) * G10 + (1/2) * F00 * G01 + (1/2) * F01 * G00
  | 3, 0 => (1/2) * G00^2 * G02
  | _, _ => 0
def heun_s_diagonal_11_supp : List (Nat × Nat) := [(1, 0), (3, 0)]

/-- `heun_s_diagonal_11` (advertised strong order 1.0): the step agrees with the Stratonovich (as Itô with drift f + ½ g g_y)–Taylor expansion in every grade ≤ 2;
    the remainder beyond grade 3 is an explicit polynomial. -/
theorem heun_s_diagonal_11_taylor (F00 F01 F02 F10 G00 G01 G02 G03 G10 G11 t0 y0 s ξ : K) :
    Gen.heun_s_diagonal_11_y1_0_0 (fun t y => F00 + F01 * (y - y0) + F02 * (y - y0)^2 + F10 * (t - t0)) (fun t y => G00 + G01 * (y - y0) + G02 * (y - y0)^2 + G03 * (y - y0)^3 + G10 * (t - t0) + G11 * (t - t0) * (y - y0)) t0 (t0 + s^2) y0 (s * ξ)
      = y0 + s * T1 G00 ξ + s^2 * T2 (strat_a00 F00 G00 G01) G00 G01 ξ + s^3 * polyXZ (heun_s_diagonal_11_Mc F00 F01 F02 F10 G00 G01 G02 G03 G10 G11) heun_s_diagonal_11_supp ξ 0
        + s^4 * ((1/2) * F10 + (1/2) * F00 * F01 + (1/2) * F00 * G11 * s * ξ + (1/2) * G00 * G11 * ξ^2 + F00 * F02 * G00 * s * ξ + F00 * G00 * G02 * ξ^2 + (1/2) * F00^2 * F02 * s^2 + (1/2) * F00^2 * G02 * s * ξ + (1/2) * F02 * G00^2 * ξ^2 + (3/2) * F00 * G00^2 * G03 * s * ξ^3 + (3/2) * F00^2 * G00 * G03 * s^2 * ξ^2 + (1/2) * F00^3 * G03 * s^3 * ξ + (1/2) * G00^3 * G03 * ξ^4) := by
  simp only [Gen.heun_s_diagonal_11_y1_0_0, T1, T2, T3, strat_a00, strat_a01, polyXZ, heun_s_diagonal_11_Mc, heun_s_diagonal_11_supp, List.map, List.sum_cons, List.sum_nil, add_sub_cancel_left]
  try (first | (field_simp; ring) | ring)

/-- `heun_s_diagonal_11`: the mean of the grade-3 coefficient equals the mean of the Taylor expansion's (so the local mean error is O(h^2.0)) -/
theorem heun_s_diagonal_11_mean (F00 F01 F02 F10 G00 G01 G02 G03 G10 G11 : K) :
    gaussE (heun_s_diagonal_11_Mc F00 F01 F02 F10 G00 G01 G02 G03 G10 G11) heun_s_diagonal_11_supp = 0 := by
  simp only [gaussE, heun_s_diagonal_11_Mc, heun_s_diagonal_11_supp, List.map, List.sum_cons, List.sum_nil, moment, mean4, strat_a00, strat_a01]
  try (first | (field_simp; ring) | ring)

/-- `heun_s_general_11`: grade-2 coefficient of the step, as a polynomial in (ξ, ζ) -/
def heun_s_general_11_Mc (F00 F01 G00 G01 G02 G10 : K) : Nat → Nat → K
  | 0, 0 => F00
  | 2, 0 => (1/2) * G00 * G01
  | _, _ => 0
def heun_s_general_11_supp : List (Nat × Nat) := [(0, 0), (2, 0)]

/-- `heun_s_general_11` (advertised strong order 0.5): the step agrees with the Stratonovich (as Itô with drift f + ½ g g_y)–Taylor expansion in every grade ≤ 1;
    the remainder beyond grade 2 is an explicit polynomial. -/
theorem heun_s_general_11_taylor (F00 F01 G00 G01 G02 G10 t0 y0 s ξ : K) :
    Gen.heun_s_general_11_y1_0_0 (fun t y => F00 + F01 * (y - y0)) (fun t y => G00 + G01 * (y - y0) + G02 * (y - y0)^2 + G10 * (t - t0)) t0 (t0 + s^2) y0 (s * ξ)
      = y0 + s * T1 G00 ξ + s^2 * polyXZ (heun_s_general_11_Mc F00 F01 G00 G01 G02 G10) heun_s_general_11_supp ξ 0
        + s^3 * ((1/2) * G10 * ξ + (1/2) * F00 * F01 * s + (1/2) * F00 * G01 * ξ + (1/2) * F01 * G00 * ξ + F00 * G00 * G02 * s * ξ^2 + (1/2) * F00^2 * G02 * s^2 * ξ + (1/2) * G00^2 * G02 * ξ^3) := by
  simp only [Gen.heun_s_general_11_y1_0_0, T1, T2, T3, strat_a00, strat_a01, polyXZ, heun_s_general_11_Mc, heun_s_general_11_supp, List.map, List.sum_cons, List.sum_nil, add_sub_cancel_left]
  try (first | (field_simp; ring) | ring)

/-- `heun_s_general_11`: the mean of the grade-2 coefficient equals the mean of the Taylor expansion's (so the local mean error is O(h^1.5)) -/
theorem heun_s_general_11_mean (F00 F01 G00 G01 G02 G10 : K) :
    gaussE (heun_s_general_11_Mc F00 F01 G00 G01 G02 G10) heun_s_general_11_supp = (strat_a00 F00 G00 G01) := by
  simp only [gaussE, heun_s_general_11_Mc, heun_s_general_11_supp, List.map, List.sum_cons, List.sum_nil, moment, mean4, strat_a00, strat_a01]
  try (first | (field_simp; ring) | ring)

/-- `heun_s_scalar_11`: grade-3 coefficient of the step, as a polynomial in (ξ, ζ) -/
def heun_s_scalar_11_Mc (F00 F01 F02 F10 G00 G01 G02 G03 G10 G11 : K) : Nat → Nat → K
  | 1, 0 => (1/2) * G10 + (1/2) * F00 * G01 + (1/2) * F01 * G00
  | 3, 0 => (1/2) * G00^2 * G02
  | _, _ => 0
def heun_s_scalar_11_supp : List (Nat × Nat) := [(1, 0), (3, 0)]

/-- `heun_s_scalar_11` (advertised strong order 1.0): the step agrees with the Stratonovich (as Itô with drift f + ½ g g_y)–Taylor expansion in every grade ≤ 2;
    the remainder beyond grade 3 is an explicit polynomial. -/
theorem heun_s_scalar_11_taylor (F00 F01 F02 F10 G00 G01 G02 G03 G10 G11 t0 y0 s ξ : K) :
    Gen.heun_s_scalar_11_y1_0_0 (fun t y => F00 + F01 * (y - y0) + F02 * (y - y0)^2 + F10 * (t - t0)) (fun t y => G00 + G01 * (y - y0) + G02 * (y - y0)^2 + G03 * (y - y0)^3 + G10 * (t - t0) + G11 * (t - t0) * (y - y0)) t0 (t0 + s^2) y0 (s * ξ)
      = y0 + s * T1 G00 ξ + s^2 * T2 (strat_a00 F00 G00 G01) G00 G01 ξ + s^3 * polyXZ (heun_s_scalar_11_Mc F00 F01 F02 F10 G00 G01 G02 G03 G10 G11) heun_s_scalar_11_supp ξ 0
        + s^4 * ((1/2) * F10 + (1/2) * F00 * F01 + (1/2) * F00 * G11 * s * ξ + (1/2) * G00 * G11 * ξ^2 + F00 * F02 * G00 * s * ξ + F00 * G00 * G02 * ξ^2 + (1/2) * F00^2 * F02 * s^2 + (1/2) * F00^2 * G02 * s * ξ + (1/2) * F02 * G00^2 * ξ^2 + (3/2) * F00 * G00^2 * G03 * s * ξ^3 + (3/2) * F00^2 * G00 * G03 * s^2 * ξ^2 + (1/2) * F00^3 * G03 * s^3 * ξ + (1/2) * G00^3 * G03 * ξ^4) := by
  simp only [Gen.heun_s_scalar_11_y1_0_0, T1, T2, T3, strat_a00, strat_a01, polyXZ, heun_s_scalar_11_Mc, heun_s_scalar_11_supp, List.map, List.sum_cons, List.sum_nil, add_sub_cancel_left]
  try (first | (field_simp; ring) | ring)

/-- `heun_s_scalar_11`: the mean of the grade-3 coefficient equals the mean of the Taylor expansion's (so the local mean error is O(h^2.0)) -/
theorem heun_s_scalar_11_mean (F00 F01 F02 F10 G00 G01 G02 G03 G10 G11 : K) :
    gaussE (heun_s_scalar_11_Mc F00 F01 F02 F10 G00 G01 G02 G03 G10 G11) heun_s_scalar_11_supp = 0 := by
  simp only [gaussE, heun_s_scalar_11_Mc, heun_s_scalar_11_supp, List.map, List.sum_cons, List.sum_nil, moment, mean4, strat_a00, strat_a01]
  try (first | (field_simp; ring) | ring)

/-- `log_ode_s_additive_11`: grade-3 coefficient of the step, as a polynomial in (ξ, ζ) -/
def log_ode_s_additive_11_Mc (F00 F01 F02 F10 G00 G10 : K) : Nat → Nat → K
  | 1, 0 => (1/2) * G10 + (1/2) * F01 * G00
  | _, _ => 0
def log_ode_s_additive_11_supp : List (Nat × Nat) := [(1, 0)]

/-- `log_ode_s_additive_11` (advertised strong order 1.0): the step agrees with the Stratonovich (as Itô with drift f + ½ g g_y)–Taylor expansion in every grade ≤ 2;
    the remainder beyond grade 3 is an explicit polynomial. -/
theorem log_ode_s_additive_11_taylor (F00 F01 F02 F10 G00 G10 t0 y0 s ξ ζ : K) :
    Gen.log_ode_s_additive_11_y1_0_0 (fun t y => F00 + F01 * (y - y0) + F02 * (y - y0)^2 + F10 * (t - t0)) (fun t => G00 + G10 * (t - t0)) t0 (t0 + s^2) y0 (s * ξ) (s^3 * ζ) 0
      = y0 + s * T1 G00 ξ + s^2 * T2 F00 G00 0 ξ + s^3 * polyXZ (log_ode_s_additive_11_Mc F00 F01 F02 F10 G00 G10) log_ode_s_additive_11_supp ξ ζ
        + s^4 * ((1/2) * F10 + (1/2) * F00 * F01 + (1/2) * F00 * F02 * G00 * s * ξ + (1/4) * F00^2 * F02 * s^2 + (1/4) * F02 * G00^2 * ξ^2) := by
  simp only [Gen.log_ode_s_additive_11_y1_0_0, T1, T2, T3, strat_a00, strat_a01, polyXZ, log_ode_s_additive_11_Mc, log_ode_s_additive_11_supp, List.map, List.sum_cons, List.sum_nil, add_sub_cancel_left]
  try (first | (field_simp; ring) | ring)

/-- `log_ode_s_additive_11`: the mean of the grade-3 coefficient equals the mean of the Taylor expansion's (so the local mean error is O(h^2.0)) -/
theorem log_ode_s_additive_11_mean (F00 F01 F02 F10 G00 G10 : K) :
    gaussE (log_ode_s_additive_11_Mc F00 F01 F02 F10 G00 G10) log_ode_s_additive_11_supp = 0 := by
  simp only [gaussE, log_ode_s_additive_11_Mc, log_ode_s_additive_11_supp, List.map, List.sum_cons, List.sum_nil, moment, mean4, strat_a00, strat_a01]
  try (first | (field_simp; ring) | ring)

/-- `log_ode_s_diagonal_11`: grade-3 coefficient of the step, as a polynomial in (ξ, ζ) -/
def log_ode_s_diagonal_11_Mc (F00 F01 F02 F10 G00 G01 G02 G03 G10 G11 : K) : Nat → Nat → K
  | 1, 0 => (1/2) * G10 + (1/2) * F00 * G01 + (1/2) * F01 * G00
  | 3, 0 => (1/4) * G00^2 * G02
  | _, _ => 0
def log_ode_s_diagonal_11_supp : List (Nat × Nat) := [(1, 0), (3, 0)]

/-- `log_ode_s_diagonal_11` (advertised strong order 1.0): the step agrees with the Stratonovich (as Itô with drift f + ½ g g_y)–Taylor expansion in every grade ≤ 2;
    the remainder beyond grade 3 is an explicit polynomial. -/
theorem log_ode_s_diagonal_11_taylor (F00 F01 F02 F10 G00 G01 G02 G03 G10 G11 t0 y0 s ξ ζ : K) :
    Gen.log_ode_s_diagonal_11_y1_0_0 (fun t y => F00 + F01 * (y - y0) + F02 * (y - y0)^2 + F10 * (t - t0)) (fun t y => G00 + G01 * (y - y0) + G02 * (y - y0)^2 + G03 * (y - y0)^3 + G10 * (t - t0) + G11 * (t - t0) * (y - y0)) t0 (t0 + s^2) y0 (s * ξ) (s^3 * ζ) 0
      = y0 + s * T1 G00 ξ + s^2 * T2 (strat_a00 F00 G00 G01) G00 G01 ξ + s^3 * polyXZ (log_ode_s_diagonal_11_Mc F00 F01 F02 F10 G00 G01 G02 G03 G10 G11) log_ode_s_diagonal_11_supp ξ ζ
        + s^4 * ((1/2) * F10 + (1/2) * F00 * F01 + (1/4) * F00 * G11 * s * ξ + (1/4) * G00 * G11 * ξ^2 + (1/2) * F00 * F02 * G00 * s * ξ + (1/2) * F00 * G00 * G02 * ξ^2 + (1/4) * F00^2 * F02 * s^2 + (1/4) * F00^2 * G02 * s * ξ + (1/4) * F02 * G00^2 * ξ^2 + (3/8) * F00 * G00^2 * G03 * s * ξ^3 + (3/8) * F00^2 * G00 * G03 * s^2 * ξ^2 + (1/8) * F00^3 * G03 * s^3 * ξ + (1/8) * G00^3 * G03 * ξ^4) := by
  simp only [Gen.log_ode_s_diagonal_11_y1_0_0, T1, T2, T3, strat_a00, strat_a01, polyXZ, log_ode_s_diagonal_11_Mc, log_ode_s_diagonal_11_supp, List.map, List.sum_cons, List.sum_nil, add_sub_cancel_left]
  try (first | (field_simp; ring) | ring)

/-- `log_ode_s_diagonal_11`: the mean of the grade-3 coefficient equals the mean of the Taylor expansion's (so the local mean error is O(h^2.0)) -/
theorem log_ode_s_diagonal_11_mean (F00 F01 F02 F10 G00 G01 G02 G03 G10 G11 : K) :
    gaussE (log_ode_s_diagonal_11_Mc F00 F01 F02 F10 G00 G01 G02 G03 G10 G11) log_ode_s_diagonal_11_supp = 0 := by
  simp only [gaussE, log_ode_s_diagonal_11_Mc, log_ode_s_diagonal_11_supp, List.map, List.sum_cons, List.sum_nil, moment, mean4, strat_a00, strat_a01]
  try (first | (field_simp; ring) | ring)

/-- `log_ode_s_general_11`: grade-2 coefficient of the step, as a polynomial in (ξ, ζ) -/
def log_ode_s_general_11_Mc (F00 F01 G00 G01 G02 G10 : K) : Nat → Nat → K
  | 0, 0 => F00
  | 2, 0 => (1/2) * G00 * G01
  | _, _ => 0
def log_ode_s_general_11_supp : List (Nat × Nat) := [(0, 0), (2, 0)]

/-- `log_ode_s_general_11` (advertised strong order 0.5): the step agrees with the Stratonovich (as Itô with drift f + ½ g g_y)–Taylor expansion in every grade ≤ 1;
    the remainder beyond grade 2 is an explicit polynomial. -/
theorem log_ode_s_general_11_taylor (F00 F01 G00 G01 G02 G10 t0 y0 s ξ ζ : K) :
    Gen.log_ode_s_general_11_y1_0_0 (fun t y => F00 + F01 * (y - y0)) (fun t y => G00 + G01 * (y - y0) + G02 * (y - y0)^2 + G10 * (t - t0)) (fun t y => G01 + 2 * G02 * (y - y0)) t0 (t0 + s^2) y0 (s * ξ) (s^3 * ζ) 0
      = y0 + s * T1 G00 ξ + s^2 * polyXZ (log_ode_s_general_11_Mc F00 F01 G00 G01 G02 G10) log_ode_s_general_11_supp ξ ζ
        + s^3 * ((1/2) * G10 * ξ + (1/2) * F00 * F01 * s + (1/2) * F00 * G01 * ξ + (1/2) * F01 * G00 * ξ + (1/2) * F00 * G00 * G02 * s * ξ^2 + (1/4) * F00^2 * G02 * s^2 * ξ + (1/4) * G00^2 * G02 * ξ^3) := by
  simp only [Gen.log_ode_s_general_11_y1_0_0, T1, T2, T3, strat_a00, strat_a01, polyXZ, log_ode_s_general_11_Mc, log_ode_s_general_11_supp, List.map, List.sum_cons, List.sum_nil, add_sub_cancel_left]
  try (first | (field_simp; ring) | ring)

/-- `log_ode_s_general_11`: the mean of the grade-2 coefficient equals the mean of the Taylor expansion's (so the local mean error is O(h^1.5)) -/
theorem log_ode_s_general_11_mean (F00 F01 G00 G01 G02 G10 : K) :
    gaussE (log_ode_s_general_11_Mc F00 F01 G00 G01 G02 G10) log_ode_s_general_11_supp = (strat_a00 F00 G00 G01) := by
  simp only [gaussE, log_ode_s_general_11_Mc, log_ode_s_general_11_supp, List.map, List.sum_cons, List.sum_nil, moment, mean4, strat_a00, strat_a01]
  try (first | (field_simp; ring) | ring)

/-- `log_ode_s_scalar_11`: grade-3 coefficient of the step, as a polynomial in (ξ, ζ) -/
def log_ode_s_scalar_11_Mc (F00 F01 F02 F10 G00 G01 G02 G03 G10 G11 : K) : Nat → Nat → K
  | 1, 0 => (1/2) * G10 + (1/2) * F00 * G01 + (1/2) * F01 * G00
  | 3, 0 => (1/4) * G00^2 * G02
  | _, _ => 0
def log_ode_s_scalar_11_supp : List (Nat × Nat) := [(1, 0), (3, 0)]

/-- `log_ode_s_scalar_11` (advertised strong order 1.0): the step agrees with the Stratonovich (as Itô with drift f + ½ g g_y)–Taylor expansion in every grade ≤ 2;
    the remainder beyond grade 3 is an explicit polynomial. -/
theorem log_ode_s_scalar_11_taylor (F00 F01 F02 F10 G00 G01 G02 G03 G10 G11 t0 y0 s ξ ζ : K) :
    Gen.log_ode_s_scalar_11_y1_0_0 (fun t y => F00 + F01 * (y - y0) + F02 * (y - y0)^2 + F10 * (t - t0)) (fun t y => G00 + G01 * (y - y0) + G02 * (y - y0)^2 + G03 * (y - y0)^3 + G10 * (t - t0) + G11 * (t - t0) * (y - y0)) t0 (t0 + s^2) y0 (s * ξ) (s^3 * ζ) 0
      = y0 + s * T1 G00 ξ + s^2 * T2 (strat_a00 F00 G00 G01) G00 G01 ξ + s^3 * polyXZ (log_ode_s_scalar_11_Mc F00 F01 F02 F10 G00 G01 G02 G03 G10 G11) log_ode_s_scalar_11_supp ξ ζ
        + s^4 * ((1/2) * F10 + (1/2) * F00 * F01 + (1/4) * F00 * G11 * s * ξ + (1/4) * G00 * G11 * ξ^2 + (1/2) * F00 * F02 * G00 * s * ξ + (1/2) * F00 * G00 * G02 * ξ^2 + (1/4) * F00^2 * F02 * s^2 + (1/4) * F00^2 * G02 * s * ξ + (1/4) * F02 * G00^2 * ξ^2 + (3/8) * F00 * G00^2 * G03 * s * ξ^3 + (3/8) * F00^2 * G00 * G03 * s^2 * ξ^2 + (1/8) * F00^3 * G03 * s^3 * ξ + (1/8) * G00^3 * G03 * ξ^4) := by
  simp only [Gen.log_ode_s_scalar_11_y1_0_0, T1, T2, T3, strat_a00, strat_a01, polyXZ, log_ode_s_scalar_11_Mc, log_ode_s_scalar_11_supp, List.map, List.sum_cons, List.sum_nil, add_sub_cancel_left]
  try (first | (field_simp; ring) | ring)

/-- `log_ode_s_scalar_11`: the mean of the grade-3 coefficient equals the mean of the Taylor expansion's (so the local mean error is O(h^2.0)) -/
theorem log_ode_s_scalar_11_mean (F00 F01 F02 F10 G00 G01 G02 G03 G10 G11 : K) :
    gaussE (log_ode_s_scalar_11_Mc F00 F01 F02 F10 G00 G01 G02 G03 G10 G11) log_ode_s_scalar_11_supp = 0 := by
  simp only [gaussE, log_ode_s_scalar_11_Mc, log_ode_s_scalar_11_supp, List.map, List.sum_cons, List.sum_nil, moment, mean4, strat_a00, strat_a01]
  try (first | (field_simp; ring) | ring)

/-- `midpoint_s_additive_11`: grade-3 coefficient of the step, as a polynomial in (ξ, ζ) -/
def midpoint_s_additive_11_Mc (F00 F01 F02 F10 G00 G10 : K) : Nat → Nat → K
  | 1, 0 => (1/2) * G10 + (1/2) * F01 * G00
  | _, _ => 0
def midpoint_s_additive_11_supp : List (Nat × Nat) := [(1, 0)]

/-- `midpoint_s_additive_11` (advertised strong order 1.0): the step agrees with the Stratonovich (as Itô with drift f + ½ g g_y)–Taylor expansion in every grade ≤ 2;
    the remainder beyond grade 3 is an explicit polynomial. -/
theorem midpoint_s_additive_11_taylor (F00 F01 F02 F10 G00 G10 t0 y0 s ξ : K) :
    Gen.midpoint_s_additive_11_y1_0_0 (fun t y => F00 + F01 * (y - y0) + F02 * (y - y0)^2 + F10 * (t - t0)) (fun t => G00 + G10 * (t - t0)) t0 (t0 + s^2) y0 (s * ξ)
      = y0 + s * T1 G00 ξ + s^2 * T2 F00 G00 0 ξ + s^3 * polyXZ (midpoint_s_additive_11_Mc F00 F01 F02 F10 G00 G10) midpoint_s_additive_11_supp ξ 0
        + s^4 * ((1/2) * F10 + (1/2) * F00 * F01 + (1/2) * F00 * F02 * G00 * s * ξ + (1/4) * F00^2 * F02 * s^2 + (1/4) * F02 * G00^2 * ξ^2) := by
  simp only [Gen.midpoint_s_additive_11_y1_0_0, T1, T2, T3, strat_a00, strat_a01, polyXZ, midpoint_s_additive_11_Mc, midpoint_s_additive_11_supp, List.map, List.sum_cons, List.sum_nil, add_sub_cancel_left]
  try (first | (field_simp; ring) | ring)

/-- `midpoint_s_additive_11`: the mean of the grade-3 coefficient equals the mean of the Taylor expansion's (so the local mean error is O(h^2.0)) -/
theorem midpoint_s_additive_11_mean (F00 F01 F02 F10 G00 G10 : K) :
    gaussE (midpoint_s_additive_11_Mc F00 F01 F02 F10 G00 G10) midpoint_s_additive_11_supp = 0 := by
  simp only [gaussE, midpoint_s_additive_11_Mc, midpoint_s_additive_11_supp, List.map, List.sum_cons, List.sum_nil, moment, mean4, strat_a00, strat_a01]
  try (first | (field_simp; ring) | ring)

/-- `midpoint_s_diagonal_11`: grade-3 coefficient of the step, as a polynomial in (ξ, ζ) -/
def midpoint_s_diagonal_11_Mc (F00 F01 F02 F10 G00 G01 G02 G03 G10 G11 : K) : Nat → Nat → K
  | 1, 0 => (1/2) * G10 + (1/2) * F00 * G01 + (1/2) * F01 * G00
  | 3, 0 => (1/4) * G00^2 * G02
  | _, _ => 0
def midpoint_s_diagonal_11_supp : List (Nat × Nat) := [(1, 0), (3, 0)]

/-- `midpoint_s_diagonal_11` (advertised strong order 1.0): the step agrees with the Stratonovich (as Itô with drift f + ½ g g_y)–Taylor expansion in every grade ≤ 2;
    the remainder beyond grade 3 is an explicit polynomial. -/
theorem midpoint_s_diagonal_11_taylor (F00 F01 F02 F10 G00 G01 G02 G03 G10 G11 t0 y0 s ξ : K) :
    Gen.midpoint_s_diagonal_11_y1_0_0 (fun t y => F00 + F01 * (y - y0) + F02 * (y - y0)^2 + F10 * (t - t0)) (fun t y => G00 + G01 * (y - y0) + G02 * (y - y0)^2 + G03 * (y - y0)^3 + G10 * (t - t0) + G11 * (t - t0) * (y - y0)) t0 (t0 + s^2) y0 (s * ξ)
      = y0 + s * T1 G00 ξ + s^2 * T2 (strat_a00 F00 G00 G01) G00 G01 ξ + s^3 * polyXZ (midpoint_s_diagonal_11_Mc F00 F01 F02 F10 G00 G01 G02 G03 G10 G11) midpoint_s_diagonal_11_supp ξ 0
        + s^4 * ((1/2) * F10 + (1/2) * F00 * F01 + (1/4) * F00 * G11 * s * ξ + (1/4) * G00 * G11 * ξ^2 + (1/2) * F00 * F02 * G00 * s * ξ + (1/2) * F00 * G00 * G02 * ξ^2 + (1/4) * F00^2 * F02 * s^2 + (1/4) * F00^2 * G02 * s * ξ + (1/4) * F02 * G00^2 * ξ^2 + (3/8) * F00 * G00^2 * G03 * s * ξ^3 + (3/8) * F00^2 * G00 * G03 * s^2 * ξ^2 + (1/8) * F00^3 * G03 * s^3 * ξ + (1/8) * G00^3 * G03 * ξ^4) := by
  simp only [Gen.midpoint_s_diagonal_11_y1_0_0, T1, T2, T3, strat_a00, strat_a01, polyXZ, midpoint_s_diagonal_11_Mc, midpoint_s_diagonal_11_supp, List.map, List.sum_cons, List.sum_nil, add_sub_cancel_left]
  try (first | (field_simp; ring) | ring)

/-- `midpoint_s_diagonal_11`: the mean of the grade-3 coefficient equals the mean of the Taylor expansion's (so the local mean error is O(h^2.0)) -/
theorem midpoint_s_diagonal_11_mean (F00 F01 F02 F10 G00 G01 G02 G03 G10 G11 : K) :
    gaussE (midpoint_s_diagonal_11_Mc F00 F01 F02 F10 G00 G01 G02 G03 G10 G11) midpoint_s_diagonal_11_supp = 0 := by
  simp only [gaussE, midpoint_s_diagonal_11_Mc, midpoint_s_diagonal_11_supp, List.map, List.sum_cons, List.sum_nil, moment, mean4, strat_a00, strat_a01]
  try (first | (field_simp; ring) | ring)

/-- `midpoint_s_general_11`: grade-2 coefficient of the step, as a polynomial in (ξ, ζ) -/
def midpoint_s_general_11_Mc (F00 F01 G00 G01 G02 G10 : K) : Nat → Nat → K
  | 0, 0 => F00
  | 2, 0 => (1/2) * G00 * G01
  | _, _ => 0
def midpoint_s_general_11_supp : List (Nat × Nat) := [(0, 0), (2, 0)]

/-- `midpoint_s_general_11` (advertised strong order 0.5): the step agrees with the Stratonovich (as Itô with drift f + ½ g g_y)–Taylor expansion in every grade ≤ 1;
    the remainder beyond grade 2 is an explicit polynomial. -/
theorem midpoint_s_general_11_taylor (F00 F01 G00 G01 G02 G10 t0 y0 s ξ : K) :
    Gen.midpoint_s_general_11_y1_0_0 (fun t y => F00 + F01 * (y - y0)) (fun t y => G00 + G01 * (y - y0) + G02 * (y - y0)^2 + G10 * (t - t0)) t0 (t0 + s^2) y0 (s * ξ)
      = y0 + s * T1 G00 ξ + s^2 * polyXZ (midpoint_s_general_11_Mc F00 F01 G00 G01 G02 G10) midpoint_s_general_11_supp ξ 0
        + s^3 * ((1/2) * G10 * ξ + (1/2) * F00 * F01 * s + (1/2) * F00 * G01 * ξ + (1/2) * F01 * G00 * ξ + (1/2) * F00 * G00 * G02 * s * ξ^2 + (1/4) * F00^2 * G02 * s^2 * ξ + (1/4) * G00^2 * G02 * ξ^3) := by
  simp only [Gen.midpoint_s_general_11_y1_0_0, T1, T2, T3, strat_a00, strat_a01, polyXZ, midpoint_s_general_11_Mc, midpoint_s_general_11_supp, List.map, List.sum_cons, List.sum_nil, add_sub_cancel_left]
  try (first | (field_simp; ring) | ring)

/-- `midpoint_s_general_11`: the mean of the grade-2 coefficient equals the mean of the Taylor expansion's (so the local mean error is O(h^1.5)) -/
theorem midpoint_s_general_11_mean (F00 F01 G00 G01 G02 G10 : K) :
    gaussE (midpoint_s_general_11_Mc F00 F01 G00 G01 G02 G10) midpoint_s_general_11_supp = (strat_a00 F00 G00 G01) := by
  simp only [gaussE, midpoint_s_general_11_Mc, midpoint_s_general_11_supp, List.map, List.sum_cons, List.sum_nil, moment, mean4, strat_a00, strat_a01]
  try (first | (field_simp; ring) | ring)

/-- `midpoint_s_scalar_11`: grade-3 coefficient of the step, as a polynomial in (ξ, ζ) -/
def midpoint_s_scalar_11_Mc (F00 F01 F02 F10 G00 G01 G02 G03 G10 G11 : K) : Nat → Nat → K
  | 1, 0 => (1/2) * G10 + (1/2) * F00 * G01 + (1/2) * F01 * G00
  | 3, 0 => (1/4) * G00^2 * G02
  | _, _ => 0
def midpoint_s_scalar_11_supp : List (Nat × Nat) := [(1, 0), (3, 0)]

/-- `midpoint_s_scalar_11` (advertised strong order 1.0): the step agrees with the Stratonovich (as Itô with drift f + ½ g g_y)–Taylor expansion in every grade ≤ 2;
    the remainder beyond grade 3 is an explicit polynomial. -/
theorem midpoint_s_scalar_11_taylor (F00 F01 F02 F10 G00 G01 G02 G03 G10 G11 t0 y0 s ξ : K) :
    Gen.midpoint_s_scalar_11_y1_0_0 (fun t y => F00 + F01 * (y - y0) + F02 * (y - y0)^2 + F10 * (t - t0)) (fun t y => G00 + G01 * (y - y0) + G02 * (y - y0)^2 + G03 * (y - y0)^3 + G10 * (t - t0) + G11 * (t - t0) * (y - y0)) t0 (t0 + s^2) y0 (s * ξ)
      = y0 + s * T1 G00 ξ + s^2 * T2 (strat_a00 F00 G00 G01) G00 G01 ξ + s^3 * polyXZ (midpoint_s_scalar_11_Mc F00 F01 F02 F10 G00 G01 G02 G03 G10 G11) midpoint_s_scalar_11_supp ξ 0
        + s^4 * ((1/2) * F10 + (1/2) * F00 * F01 + (1/4) * F00 * G11 * s * ξ + (1/4) * G00 * G11 * ξ^2 + (1/2) * F00 * F02 * G00 * s * ξ + (1/2) * F00 * G00 * G02 * ξ^2 + (1/4) * F00^2 * F02 * s^2 + (1/4) * F00^2 * G02 * s * ξ + (1/4) * F02 * G00^2 * ξ^2 + (3/8) * F00 * G00^2 * G03 * s * ξ^3 + (3/8) * F00^2 * G00 * G03 * s^2 * ξ^2 + (1/8) * F00^3 * G03 * s^3 * ξ + (1/8) * G00^3 * G03 * ξ^4) := by
  simp only [Gen.midpoint_s_scalar_11_y1_0_0, T1, T2, T3, strat_a00, strat_a01, polyXZ, midpoint_s_scalar_11_Mc, midpoint_s_scalar_11_supp, List.map, List.sum_cons, List.sum_nil, add_sub_cancel_left]
  try (first | (field_simp; ring) | ring)

/-- `midpoint_s_scalar_11`: the mean of the grade-3 coefficient equals the mean of the Taylor expansion's (so the local mean error is O(h^2.0)) -/
theorem midpoint_s_scalar_11_mean (F00 F01 F02 F10 G00 G01 G02 G03 G10 G11 : K) :
    gaussE (midpoint_s_scalar_11_Mc F00 F01 F02 F10 G00 G01 G02 G03 G10 G11) midpoint_s_scalar_11_supp = 0 := by
  simp only [gaussE, midpoint_s_scalar_11_Mc, midpoint_s_scalar_11_supp, List.map, List.sum_cons, List.sum_nil, moment, mean4, strat_a00, strat_a01]
  try (first | (field_simp; ring) | ring)

/-- `milstein_i_additive_11`: grade-3 coefficient of the step, as a polynomial in (ξ, ζ) -/
def milstein_i_additive_11_Mc (F00 F01 F02 F10 G00 G10 : K) : Nat → Nat → K
  | _, _ => 0
def milstein_i_additive_11_supp : List (Nat × Nat) := []

/-- `milstein_i_additive_11` (advertised strong order 1.0): the step agrees with the Itô–Taylor expansion in every grade ≤ 2;
    the remainder beyond grade 3 is an explicit polynomial. -/
theorem milstein_i_additive_11_taylor (F00 F01 F02 F10 G00 G10 t0 y0 s ξ : K) :
    Gen.milstein_i_additive_11_y1_0_0 (fun t y => F00 + F01 * (y - y0) + F02 * (y - y0)^2 + F10 * (t - t0)) (fun t => G00 + G10 * (t - t0)) t0 (t0 + s^2) y0 (s * ξ)
      = y0 + s * T1 G00 ξ + s^2 * T2 F00 G00 0 ξ + s^3 * polyXZ (milstein_i_additive_11_Mc F00 F01 F02 F10 G00 G10) milstein_i_additive_11_supp ξ 0
        + s^4 * (0) := by
  simp only [Gen.milstein_i_additive_11_y1_0_0, T1, T2, T3, strat_a00, strat_a01, polyXZ, milstein_i_additive_11_Mc, milstein_i_additive_11_supp, List.map, List.sum_cons, List.sum_nil, add_sub_cancel_left]
  try (first | (field_simp; ring) | ring)

/-- `milstein_i_additive_11`: the mean of the grade-3 coefficient equals the mean of the Taylor expansion's (so the local mean error is O(h^2.0)) -/
theorem milstein_i_additive_11_mean (F00 F01 F02 F10 G00 G10 : K) :
    gaussE (milstein_i_additive_11_Mc F00 F01 F02 F10 G00 G10) milstein_i_additive_11_supp = 0 := by
  simp only [gaussE, milstein_i_additive_11_Mc, milstein_i_additive_11_supp, List.map, List.sum_cons, List.sum_nil, moment, mean4, strat_a00, strat_a01]
  try (first | (field_simp; ring) | ring)

/-- `milstein_i_diagonal_11`: grade-3 coefficient of the step, as a polynomial in (ξ, ζ) -/
def milstein_i_diagonal_11_Mc (F00 F01 F02 F10 G00 G01 G02 G03 G10 G11 : K) : Nat → Nat → K
  | _, _ => 0
def milstein_i_diagonal_11_supp : List (Nat × Nat) := []

/-- `milstein_i_diagonal_11` (advertised strong order 1.0): the step agrees with the Itô–Taylor expansion in every grade ≤ 2;
    the remainder beyond grade 3 is an explicit polynomial. -/
theorem milstein_i_diagonal_11_taylor (F00 F01 F02 F10 G00 G01 G02 G03 G10 G11 t0 y0 s ξ : K) :
    Gen.milstein_i_diagonal_11_y1_0_0 (fun t y => F00 + F01 * (y - y0) + F02 * (y - y0)^2 + F10 * (t - t0)) (fun t y => G00 + G01 * (y - y0) + G02 * (y - y0)^2 + G03 * (y - y0)^3 + G10 * (t - t0) + G11 * (t - t0) * (y - y0)) (fun t y => G01 + 2 * G02 * (y - y0) + 3 * G03 * (y - y0)^2 + G11 * (t - t0)) t0 (t0 + s^2) y0 (s * ξ)
      = y0 + s * T1 G00 ξ + s^2 * T2 F00 G00 G01 ξ + s^3 * polyXZ (milstein_i_diagonal_11_Mc F00 F01 F02 F10 G00 G01 G02 G03 G10 G11) milstein_i_diagonal_11_supp ξ 0
        + s^4 * (0) := by
  simp only [Gen.milstein_i_diagonal_11_y1_0_0, T1, T2, T3, strat_a00, strat_a01, polyXZ, milstein_i_diagonal_11_Mc, milstein_i_diagonal_11_supp, List.map, List.sum_cons, List.sum_nil, add_sub_cancel_left]
  try (first | (field_simp; ring) | ring)

/-- `milstein_i_diagonal_11`: the mean of the grade-3 coefficient equals the mean of the Taylor expansion's (so the local mean error is O(h^2.0)) -/
theorem milstein_i_diagonal_11_mean (F00 F01 F02 F10 G00 G01 G02 G03 G10 G11 : K) :
    gaussE (milstein_i_diagonal_11_Mc F00 F01 F02 F10 G00 G01 G02 G03 G10 G11) milstein_i_diagonal_11_supp = 0 := by
  simp only [gaussE, milstein_i_diagonal_11_Mc, milstein_i_diagonal_11_supp, List.map, List.sum_cons, List.sum_nil, moment, mean4, strat_a00, strat_a01]
  try (first | (field_simp; ring) | ring)

/-- `milstein_i_diagonal_11_gf`: grade-3 coefficient of the step, as a polynomial in (ξ, ζ) -/
def milstein_i_diagonal_11_gf_Mc (F00 F01 F02 F10 G00 G01 G02 G03 G10 G11 : K) : Nat → Nat → K
  | 0, 0 => (-1/2) * F00 * G01 + (-1/2) * G00^2 * G02
  | 2, 0 => (1/2) * F00 * G01 + (1/2) * G00^2 * G02
  | _, _ => 0
def milstein_i_diagonal_11_gf_supp : List (Nat × Nat) := [(0, 0), (2, 0)]

/-- `milstein_i_diagonal_11_gf` (advertised strong order 1.0): the step agrees with the Itô–Taylor expansion in every grade ≤ 2;
    the remainder beyond grade 3 is an explicit polynomial. -/
theorem milstein_i_diagonal_11_gf_taylor (sqrt : K → K) (F00 F01 F02 F10 G00 G01 G02 G03 G10 G11 t0 y0 s ξ : K) (hs : s ≠ 0) (hsq : sqrt (s ^ 2) = s) :
    Gen.milstein_i_diagonal_11_gf_y1_0_0 sqrt (fun t y => F00 + F01 * (y - y0) + F02 * (y - y0)^2 + F10 * (t - t0)) (fun t y => G00 + G01 * (y - y0) + G02 * (y - y0)^2 + G03 * (y - y0)^3 + G10 * (t - t0) + G11 * (t - t0) * (y - y0)) t0 (t0 + s^2) y0 (s * ξ)
      = y0 + s * T1 G00 ξ + s^2 * T2 F00 G00 G01 ξ + s^3 * polyXZ (milstein_i_diagonal_11_gf_Mc F00 F01 F02 F10 G00 G01 G02 G03 G10 G11) milstein_i_diagonal_11_gf_supp ξ 0
        + s^4 * ((-1) * F00 * G00 * G02 + (-1/2) * F00^2 * G02 * s + (-1/2) * G00^3 * G03 + F00 * G00 * G02 * ξ^2 + (-3/2) * F00 * G00^2 * G03 * s + (-3/2) * F00^2 * G00 * G03 * s^2 + (1/2) * F00^2 * G02 * s * ξ^2 + (1/2) * G00^3 * G03 * ξ^2 + (3/2) * F00 * G00^2 * G03 * s * ξ^2 + (-1/2) * F00^3 * G03 * s^3 + (3/2) * F00^2 * G00 * G03 * s^2 * ξ^2 + (1/2) * F00^3 * G03 * s^3 * ξ^2) := by
  simp only [Gen.milstein_i_diagonal_11_gf_y1_0_0, T1, T2, T3, strat_a00, strat_a01, polyXZ, milstein_i_diagonal_11_gf_Mc, milstein_i_diagonal_11_gf_supp, List.map, List.sum_cons, List.sum_nil, add_sub_cancel_left, hsq]
  try (first | (field_simp; ring) | ring)

/-- `milstein_i_diagonal_11_gf`: the mean of the grade-3 coefficient equals the mean of the Taylor expansion's (so the local mean error is O(h^2.0)) -/
theorem milstein_i_diagonal_11_gf_mean (F00 F01 F02 F10 G00 G01 G02 G03 G10 G11 : K) :
    gaussE (milstein_i_diagonal_11_gf_Mc F00 F01 F02 F10 G00 G01 G02 G03 G10 G11) milstein_i_diagonal_11_gf_supp = 0 := by
  simp only [gaussE, milstein_i_diagonal_11_gf_Mc, milstein_i_diagonal_11_gf_supp, List.map, List.sum_cons, List.sum_nil, moment, mean4, strat_a00, strat_a01]
  try (first | (field_simp; ring) | ring)

/-- `milstein_i_scalar_11`: grade-3 coefficient of the step, as a polynomial in (ξ, ζ) -/
def milstein_i_scalar_11_Mc (F00 F01 F02 F10 G00 G01 G02 G03 G10 G11 : K) : Nat → Nat → K
  | _, _ => 0
def milstein_i_scalar_11_supp : List (Nat × Nat) := []

/-- `milstein_i_scalar_11` (advertised strong order 1.0): the step agrees with the Itô–Taylor expansion in every grade ≤ 2;
    the remainder beyond grade 3 is an explicit polynomial. -/
theorem milstein_i_scalar_11_taylor (F00 F01 F02 F10 G00 G01 G02 G03 G10 G11 t0 y0 s ξ : K) :
    Gen.milstein_i_scalar_11_y1_0_0 (fun t y => F00 + F01 * (y - y0) + F02 * (y - y0)^2 + F10 * (t - t0)) (fun t y => G00 + G01 * (y - y0) + G02 * (y - y0)^2 + G03 * (y - y0)^3 + G10 * (t - t0) + G11 * (t - t0) * (y - y0)) (fun t y => G01 + 2 * G02 * (y - y0) + 3 * G03 * (y - y0)^2 + G11 * (t - t0)) t0 (t0 + s^2) y0 (s * ξ)
      = y0 + s * T1 G00 ξ + s^2 * T2 F00 G00 G01 ξ + s^3 * polyXZ (milstein_i_scalar_11_Mc F00 F01 F02 F10 G00 G01 G02 G03 G10 G11) milstein_i_scalar_11_supp ξ 0
        + s^4 * (0) := by
  simp only [Gen.milstein_i_scalar_11_y1_0_0, T1, T2, T3, strat_a00, strat_a01, polyXZ, milstein_i_scalar_11_Mc, milstein_i_scalar_11_supp, List.map, List.sum_cons, List.sum_nil, add_sub_cancel_left]
  try (first | (field_simp; ring) | ring)

/-- `milstein_i_scalar_11`: the mean of the grade-3 coefficient equals the mean of the Taylor expansion's (so the local mean error is O(h^2.0)) -/
theorem milstein_i_scalar_11_mean (F00 F01 F02 F10 G00 G01 G02 G03 G10 G11 : K) :
    gaussE (milstein_i_scalar_11_Mc F00 F01 F02 F10 G00 G01 G02 G03 G10 G11) milstein_i_scalar_11_supp = 0 := by
  simp only [gaussE, milstein_i_scalar_11_Mc, milstein_i_scalar_11_supp, List.map, List.sum_cons, List.sum_nil, moment, mean4, strat_a00, strat_a01]
  try (first | (field_simp; ring) | ring)

/-- `milstein_i_scalar_11_gf`: grade-3 coefficient of the step, as a polynomial in (ξ, ζ) -/
def milstein_i_scalar_11_gf_Mc (F00 F01 F02 F10 G00 G01 G02 G03 G10 G11 : K) : Nat → Nat → K
  | 0, 0 => (-1/2) * F00 * G01 + (-1/2) * G00^2 * G02
  | 2, 0 => (1/2) * F00 * G01 + (1/2) * G00^2 * G02
  | _, _ => 0
def milstein_i_scalar_11_gf_supp : List (Nat × Nat) := [(0, 0), (2, 0)]

/-- `milstein_i_scalar_11_gf` (advertised strong order 1.0): the step agrees with the Itô–Taylor expansion in every grade ≤ 2;
    the remainder beyond grade 3 is an explicit polynomial. -/
theorem milstein_i_scalar_11_gf_taylor (sqrt : K → K) (F00 F01 F02 F10 G00 G01 G02 G03 G10 G11 t0 y0 s ξ : K) (hs : s ≠ 0) (hsq : sqrt (s ^ 2) = s) :
    Gen.milstein_i_scalar_11_gf_y1_0_0 sqrt (fun t y => F00 + F01 * (y - y0) + F02 * (y - y0)^2 + F10 * (t - t0)) (fun t y => G00 + G01 * (y - y0) + G02 * (y - y0)^2 + G03 * (y - y0)^3 + G10 * (t - t0) + G11 * (t - t0) * (y - y0)) t0 (t0 + s^2) y0 (s * ξ)
      = y0 + s * T1 G00 ξ + s^2 * T2 F00 G00 G01 ξ + s^3 * polyXZ (milstein_i_scalar_11_gf_Mc F00 F01 F02 F10 G00 G01 G02 G03 G10 G11) milstein_i_scalar_11_gf_supp ξ 0
        + s^4 * ((-1) * F00 * G00 * G02 + (-1/2) * F00^2 * G02 * s + (-1/2) * G00^3 * G03 + F00 * G00 * G02 * ξ^2 + (-3/2) * F00 * G00^2 * G03 * s + (-3/2) * F00^2 * G00 * G03 * s^2 + (1/2) * F00^2 * G02 * s * ξ^2 + (1/2) * G00^3 * G03 * ξ^2 + (3/2) * F00 * G00^2 * G03 * s * ξ^2 + (-1/2) * F00^3 * G03 * s^3 + (3/2) * F00^2 * G00 * G03 * s^2 * ξ^2 + (1/2) * F00^3 * G03 * s^3 * ξ^2) := by
  simp only [Gen.milstein_i_scalar_11_gf_y1_0_0, T1, T2, T3, strat_a00, strat_a01, polyXZ, milstein_i_scalar_11_gf_Mc, milstein_i_scalar_11_gf_supp, List.map, List.sum_cons, List.sum_nil, add_sub_cancel_left, hsq]
  try (first | (field_simp; ring) | ring)

/-- `milstein_i_scalar_11_gf`: the mean of the grade-3 coefficient equals the mean of the Taylor expansion's (so the local mean error is O(h^2.0)) -/
theorem milstein_i_scalar_11_gf_mean (F00 F01 F02 F10 G00 G01 G02 G03 G10 G11 : K) :
    gaussE (milstein_i_scalar_11_gf_Mc F00 F01 F02 F10 G00 G01 G02 G03 G10 G11) milstein_i_scalar_11_gf_supp = 0 := by
  simp only [gaussE, milstein_i_scalar_11_gf_Mc, milstein_i_scalar_11_gf_supp, List.map, List.sum_cons, List.sum_nil, moment, mean4, strat_a00, strat_a01]
  try (first | (field_simp; ring) | ring)

/-- `milstein_s_additive_11`: grade-3 coefficient of the step, as a polynomial in (ξ, ζ) -/
def milstein_s_additive_11_Mc (F00 F01 F02 F10 G00 G10 : K) : Nat → Nat → K
  | _, _ => 0
def milstein_s_additive_11_supp : List (Nat × Nat) := []

/-- `milstein_s_additive_11` (advertised strong order 1.0): the step agrees with the Stratonovich (as Itô with drift f + ½ g g_y)–Taylor expansion in every grade ≤ 2;
    the remainder beyond grade 3 is an explicit polynomial. -/
theorem milstein_s_additive_11_taylor (F00 F01 F02 F10 G00 G10 t0 y0 s ξ : K) :
    Gen.milstein_s_additive_11_y1_0_0 (fun t y => F00 + F01 * (y - y0) + F02 * (y - y0)^2 + F10 * (t - t0)) (fun t => G00 + G10 * (t - t0)) t0 (t0 + s^2) y0 (s * ξ)
      = y0 + s * T1 G00 ξ + s^2 * T2 F00 G00 0 ξ + s^3 * polyXZ (milstein_s_additive_11_Mc F00 F01 F02 F10 G00 G10) milstein_s_additive_11_supp ξ 0
        + s^4 * (0) := by
  simp only [Gen.milstein_s_additive_11_y1_0_0, T1, T2, T3, strat_a00, strat_a01, polyXZ, milstein_s_additive_11_Mc, milstein_s_additive_11_supp, List.map, List.sum_cons, List.sum_nil, add_sub_cancel_left]
  try (first | (field_simp; ring) | ring)

/-- `milstein_s_additive_11`: the mean of the grade-3 coefficient equals the mean of the Taylor expansion's (so the local mean error is O(h^2.0)) -/
theorem milstein_s_additive_11_mean (F00 F01 F02 F10 G00 G10 : K) :
    gaussE (milstein_s_additive_11_Mc F00 F01 F02 F10 G00 G10) milstein_s_additive_11_supp = 0 := by
  simp only [gaussE, milstein_s_additive_11_Mc, milstein_s_additive_11_supp, List.map, List.sum_cons, List.sum_nil, moment, mean4, strat_a00, strat_a01]
  try (first | (field_simp; ring) | ring)

/-- `milstein_s_diagonal_11`: grade-3 coefficient of the step, as a polynomial in (ξ, ζ) -/
def milstein_s_diagonal_11_Mc (F00 F01 F02 F10 G00 G01 G02 G03 G10 G11 : K) : Nat → Nat → K
  | _, _ => 0
def milstein_s_diagonal_11_supp : List (Nat × Nat) := []

/-- `milstein_s_diagonal_11` (advertised strong order 1.0): the step agrees with the Stratonovich (as Itô with drift f + ½ g g_y)–Taylor expansion in every grade ≤ 2;
    the remainder beyond grade 3 is an explicit polynomial. -/
theorem milstein_s_diagonal_11_taylor (F00 F01 F02 F10 G00 G01 G02 G03 G10 G11 t0 y0 s ξ : K) :
    Gen.milstein_s_diagonal_11_y1_0_0 (fun t y => F00 + F01 * (y - y0) + F02 * (y - y0)^2 + F10 * (t - t0)) (fun t y => G00 + G01 * (y - y0) + G02 * (y - y0)^2 + G03 * (y - y0)^3 + G10 * (t - t0) + G11 * (t - t0) * (y - y0)) (fun t y => G01 + 2 * G02 * (y - y0) + 3 * G03 * (y - y0)^2 + G11 * (t - t0)) t0 (t0 + s^2) y0 (s * ξ)
      = y0 + s * T1 G00 ξ + s^2 * T2 (strat_a00 F00 G00 G01) G00 G01 ξ + s^3 * polyXZ (milstein_s_diagonal_11_Mc F00 F01 F02 F10 G00 G01 G02 G03 G10 G11) milstein_s_diagonal_11_supp ξ 0
        + s^4 * (0) := by
  simp only [Gen.milstein_s_diagonal_11_y1_0_0, T1, T2, T3, strat_a00, strat_a01, polyXZ, milstein_s_diagonal_11_Mc, milstein_s_diagonal_11_supp, List.map, List.sum_cons, List.sum_nil, add_sub_cancel_left]
  try (first | (field_simp; ring) | ring)

/-- `milstein_s_diagonal_11`: the mean of the grade-3 coefficient equals the mean of the Taylor expansion's (so the local mean error is O(h^2.0)) -/
theorem milstein_s_diagonal_11_mean (F00 F01 F02 F10 G00 G01 G02 G03 G10 G11 : K) :
    gaussE (milstein_s_diagonal_11_Mc F00 F01 F02 F10 G00 G01 G02 G03 G10 G11) milstein_s_diagonal_11_supp = 0 := by
  simp only [gaussE, milstein_s_diagonal_11_Mc, milstein_s_diagonal_11_supp, List.map, List.sum_cons, List.sum_nil, moment, mean4, strat_a00, strat_a01]
  try (first | (field_simp; ring) | ring)

/-- `milstein_s_diagonal_11_gf`: grade-3 coefficient of the step, as a polynomial in (ξ, ζ) -/
def milstein_s_diagonal_11_gf_Mc (F00 F01 F02 F10 G00 G01 G02 G03 G10 G11 : K) : Nat → Nat → K
  | _, _ => 0
def milstein_s_diagonal_11_gf_supp : List (Nat × Nat) := []

/-- `milstein_s_diagonal_11_gf` (advertised strong order 1.0): the step agrees with the Stratonovich (as Itô with drift f + ½ g g_y)–Taylor expansion in every grade ≤ 2;
    the remainder beyond grade 3 is an explicit polynomial. -/
theorem milstein_s_diagonal_11_gf_taylor (sqrt : K → K) (F00 F01 F02 F10 G00 G01 G02 G03 G10 G11 t0 y0 s ξ : K) (hs : s ≠ 0) (hsq : sqrt (s ^ 2) = s) :
    Gen.milstein_s_diagonal_11_gf_y1_0_0 sqrt (fun t y => F00 + F01 * (y - y0) + F02 * (y - y0)^2 + F10 * (t - t0)) (fun t y => G00 + G01 * (y - y0) + G02 * (y - y0)^2 + G03 * (y - y0)^3 + G10 * (t - t0) + G11 * (t - t0) * (y - y0)) t0 (t0 + s^2) y0 (s * ξ)
      = y0 + s * T1 G00 ξ + s^2 * T2 (strat_a00 F00 G00 G01) G00 G01 ξ + s^3 * polyXZ (milstein_s_diagonal_11_gf_Mc F00 F01 F02 F10 G00 G01 G02 G03 G10 G11) milstein_s_diagonal_11_gf_supp ξ 0
        + s^4 * ((1/2) * G00^3 * G03 * ξ^2) := by
  simp only [Gen.milstein_s_diagonal_11_gf_y1_0_0, T1, T2, T3, strat_a00, strat_a01, polyXZ, milstein_s_diagonal_11_gf_Mc, milstein_s_diagonal_11_gf_supp, List.map, List.sum_cons, List.sum_nil, add_sub_cancel_left, hsq]
  try (first | (field_simp; ring) | ring)

/-- `milstein_s_diagonal_11_gf`: the mean of the grade-3 coefficient equals the mean of the Taylor expansion's (so the local mean error is O(h^2.0)) -/
theorem milstein_s_diagonal_11_gf_mean (F00 F01 F02 F10 G00 G01 G02 G03 G10 G11 : K) :
    gaussE (milstein_s_diagonal_11_gf_Mc F00 F01 F02 F10 G00 G01 G02 G03 G10 G11) milstein_s_diagonal_11_gf_supp = 0 := by
  simp only [gaussE, milstein_s_diagonal_11_gf_Mc, milstein_s_diagonal_11_gf_supp, List.map, List.sum_cons, List.sum_nil, moment, mean4, strat_a00, strat_a01]
  try (first | (field_simp; ring) | ring)

/-- `milstein_s_scalar_11`: grade-3 coefficient of the step, as a polynomial in (ξ, ζ) -/
def milstein_s_scalar_11_Mc (F00 F01 F02 F10 G00 G01 G02 G03 G10 G11 : K) : Nat → Nat → K
  | _, _ => 0
def milstein_s_scalar_11_supp : List (Nat × Nat) := []

/-- `milstein_s_scalar_11` (advertised strong order 1.0): the step agrees with the Stratonovich (as Itô with drift f + ½ g g_y)–Taylor expansion in every grade ≤ 2;
    the remainder beyond grade 3 is an explicit polynomial. -/
theorem milstein_s_scalar_11_taylor (F00 F01 F02 F10 G00 G01 G02 G03 G10 G11 t0 y0 s ξ : K) :
    Gen.milstein_s_scalar_11_y1_0_0 (fun t y => F00 + F01 * (y - y0) + F02 * (y - y0)^2 + F10 * (t - t0)) (fun t y => G00 + G01 * (y - y0) + G02 * (y - y0)^2 + G03 * (y - y0)^3 + G10 * (t - t0) + G11 * (t - t0) * (y - y0)) (fun t y => G01 + 2 * G02 * (y - y0) + 3 * G03 * (y - y0)^2 + G11 * (t - t0)) t0 (t0 + s^2) y0 (s * ξ)
      = y0 + s * T1 G00 ξ + s^2 * T2 (strat_a00 F00 G00 G01) G00 G01 ξ + s^3 * polyXZ (milstein_s_scalar_11_Mc F00 F01 F02 F10 G00 G01 G02 G03 G10 G11) milstein_s_scalar_11_supp ξ 0
        + s^4 * (0) := by
  simp only [Gen.milstein_s_scalar_11_y1_0_0, T1, T2, T3, strat_a00, strat_a01, polyXZ, milstein_s_scalar_11_Mc, milstein_s_scalar_11_supp, List.map, List.sum_cons, List.sum_nil, add_sub_cancel_left]
  try (first | (field_simp; ring) | ring)

/-- `milstein_s_scalar_11`: the mean of the grade-3 coefficient equals the mean of the Taylor expansion's (so the local mean error is O(h^2.0)) -/
theorem milstein_s_scalar_11_mean (F00 F01 F02 F10 G00 G01 G02 G03 G10 G11 : K) :
    gaussE (milstein_s_scalar_11_Mc F00 F01 F02 F10 G00 G01 G02 G03 G10 G11) milstein_s_scalar_11_supp = 0 := by
  simp only [gaussE, milstein_s_scalar_11_Mc, milstein_s_scalar_11_supp, List.map, List.sum_cons, List.sum_nil, moment, mean4, strat_a00, strat_a01]
  try (first | (field_simp; ring) | ring)

/-- `milstein_s_scalar_11_gf`: grade-3 coefficient of the step, as a polynomial in (ξ, ζ) -/
def milstein_s_scalar_11_gf_Mc (F00 F01 F02 F10 G00 G01 G02 G03 G10 G11 : K) : Nat → Nat → K
  | _, _ => 0
def milstein_s_scalar_11_gf_supp : List (Nat × Nat) := []

/-- `milstein_s_scalar_11_gf` (advertised strong order 1.0): the step agrees with the Stratonovich (as Itô with drift f + ½ g g_y)–Taylor expansion in every grade ≤ 2;
    the remainder beyond grade 3 is an explicit polynomial. -/
theorem milstein_s_scalar_11_gf_taylor (sqrt : K → K) (F00 F01 F02 F10 G00 G01 G02 G03 G10 G11 t0 y0 s ξ : K) (hs : s ≠ 0) (hsq : sqrt (s ^ 2) = s) :
    Gen.milstein_s_scalar_11_gf_y1_0_0 sqrt (fun t y => F00 + F01 * (y - y0) + F02 * (y - y0)^2 + F10 * (t - t0)) (fun t y => G00 + G01 * (y - y0) + G02 * (y - y0)^2 + G03 * (y - y0)^3 + G10 * (t - t0) + G11 * (t - t0) * (y - y0)) t0 (t0 + s^2) y0 (s * ξ)
      = y0 + s * T1 G00 ξ + s^2 * T2 (strat_a00 F00 G00 G01) G00 G01 ξ + s^3 * polyXZ (milstein_s_scalar_11_gf_Mc F00 F01 F02 F10 G00 G01 G02 G03 G10 G11) milstein_s_scalar_11_gf_supp ξ 0
        + s^4 * ((1/2) * G00^3 * G03 * ξ^2) := by
  simp only [Gen.milstein_s_scalar_11_gf_y1_0_0, T1, T2, T3, strat_a00, strat_a01, polyXZ, milstein_s_scalar_11_gf_Mc, milstein_s_scalar_11_gf_supp, List.map, List.sum_cons, List.sum_nil, add_sub_cancel_left, hsq]
  try (first | (field_simp; ring) | ring)

/-- `milstein_s_scalar_11_gf`: the mean of the grade-3 coefficient equals the mean of the Taylor expansion's (so the local mean error is O(h^2.0)) -/
theorem milstein_s_scalar_11_gf_mean (F00 F01 F02 F10 G00 G01 G02 G03 G10 G11 : K) :
    gaussE (milstein_s_scalar_11_gf_Mc F00 F01 F02 F10 G00 G01 G02 G03 G10 G11) milstein_s_scalar_11_gf_supp = 0 := by
  simp only [gaussE, milstein_s_scalar_11_gf_Mc, milstein_s_scalar_11_gf_supp, List.map, List.sum_cons, List.sum_nil, moment, mean4, strat_a00, strat_a01]
  try (first | (field_simp; ring) | ring)

/-- `reversible_heun_s_additive_11`: grade-3 coefficient of the step, as a polynomial in (ξ, ζ) -/
def reversible_heun_s_additive_11_Mc (F00 F01 F02 F10 G00 G10 : K) : Nat → Nat → K
  | 1, 0 => (1/2) * G10 + (1/2) * F01 * G00
  | _, _ => 0
def reversible_heun_s_additive_11_supp : List (Nat × Nat) := [(1, 0)]

/-- `reversible_heun_s_additive_11` (advertised strong order 1.0): the step agrees with the Stratonovich (as Itô with drift f + ½ g g_y)–Taylor expansion in every grade ≤ 2;
    the remainder beyond grade 3 is an explicit polynomial. -/
theorem reversible_heun_s_additive_11_taylor (F00 F01 F02 F10 G00 G10 t0 y0 s ξ : K) :
    Gen.reversible_heun_s_additive_11_y1_0_0 (fun t y => F00 + F01 * (y - y0) + F02 * (y - y0)^2 + F10 * (t - t0)) (fun t => G00 + G10 * (t - t0)) t0 (t0 + s^2) y0 (s * ξ) y0 F00 G00
      = y0 + s * T1 G00 ξ + s^2 * T2 F00 G00 0 ξ + s^3 * polyXZ (reversible_heun_s_additive_11_Mc F00 F01 F02 F10 G00 G10) reversible_heun_s_additive_11_supp ξ 0
        + s^4 * ((1/2) * F10 + (1/2) * F00 * F01 + F00 * F02 * G00 * s * ξ + (1/2) * F00^2 * F02 * s^2 + (1/2) * F02 * G00^2 * ξ^2) := by
  simp only [Gen.reversible_heun_s_additive_11_y1_0_0, T1, T2, T3, strat_a00, strat_a01, polyXZ, reversible_heun_s_additive_11_Mc, reversible_heun_s_additive_11_supp, List.map, List.sum_cons, List.sum_nil, add_sub_cancel_left]
  try (first | (field_simp; ring) | ring)

/-- `reversible_heun_s_additive_11`: the mean of the grade-3 coefficient equals the mean of the Taylor expansion's (so the local mean error is O(h^2.0)) -/
theorem reversible_heun_s_additive_11_mean (F00 F01 F02 F10 G00 G10 : K) :
    gaussE (reversible_heun_s_additive_11_Mc F00 F01 F02 F10 G00 G10) reversible_heun_s_additive_11_supp = 0 := by
  simp only [gaussE, reversible_heun_s_additive_11_Mc, reversible_heun_s_additive_11_supp, List.map, List.sum_cons, List.sum_nil, moment, mean4, strat_a00, strat_a01]
  try (first | (field_simp; ring) | ring)

/-- `reversible_heun_s_diagonal_11`: grade-2 coefficient of the step, as a polynomial in (ξ, ζ) -/
def reversible_heun_s_diagonal_11_Mc (F00 F01 G00 G01 G02 G10 : K) : Nat → Nat → K
  | 0, 0 => F00
  | 2, 0 => (1/2) * G00 * G01
  | _, _ => 0
def reversible_heun_s_diagonal_11_supp : List (Nat × Nat) := [(0, 0), (2, 0)]

/-- `reversible_heun_s_diagonal_11` (advertised strong order 0.5): the step agrees with the Stratonovich (as Itô with drift f + ½ g g_y)–Taylor expansion in every grade ≤ 1;
    the remainder beyond grade 2 is an explicit polynomial. -/
theorem reversible_heun_s_diagonal_11_taylor (F00 F01 G00 G01 G02 G10 t0 y0 s ξ : K) :
    Gen.reversible_heun_s_diagonal_11_y1_0_0 (fun t y => F00 + F01 * (y - y0)) (fun t y => G00 + G01 * (y - y0) + G02 * (y - y0)^2 + G10 * (t - t0)) t0 (t0 + s^2) y0 (s * ξ) y0 F00 G00
      = y0 + s * T1 G00 ξ + s^2 * polyXZ (reversible_heun_s_diagonal_11_Mc F00 F01 G00 G01 G02 G10) reversible_heun_s_diagonal_11_supp ξ 0
        + s^3 * ((1/2) * G10 * ξ + (1/2) * F00 * F01 * s + (1/2) * F00 * G01 * ξ + (1/2) * F01 * G00 * ξ + F00 * G00 * G02 * s * ξ^2 + (1/2) * F00^2 * G02 * s^2 * ξ + (1/2) * G00^2 * G02 * ξ^3) := by
  simp only [Gen.reversible_heun_s_diagonal_11_y1_0_0, T1, T2, T3, strat_a00, strat_a01, polyXZ, reversible_heun_s_diagonal_11_Mc, reversible_heun_s_diagonal_11_supp, List.map, List.sum_cons, List.sum_nil, add_sub_cancel_left]
  try (first | (field_simp; ring) | ring)

/-- `reversible_heun_s_diagonal_11`: the mean of the grade-2 coefficient equals the mean of the Taylor expansion's (so the local mean error is O(h^1.5)) -/
theorem reversible_heun_s_diagonal_11_mean (F00 F01 G00 G01 G02 G10 : K) :
    gaussE (reversible_heun_s_diagonal_11_Mc F00 F01 G00 G01 G02 G10) reversible_heun_s_diagonal_11_supp = (strat_a00 F00 G00 G01) := by
  simp only [gaussE, reversible_heun_s_diagonal_11_Mc, reversible_heun_s_diagonal_11_supp, List.map, List.sum_cons, List.sum_nil, moment, mean4, strat_a00, strat_a01]
  try (first | (field_simp; ring) | ring)

/-- `reversible_heun_s_general_11`: grade-2 coefficient of the step, as a polynomial in (ξ, ζ) -/
def reversible_heun_s_general_11_Mc (F00 F01 G00 G01 G02 G10 : K) : Nat → Nat → K
  | 0, 0 => F00
  | 2, 0 => (1/2) * G00 * G01
  | _, _ => 0
def reversible_heun_s_general_11_supp : List (Nat × Nat) := [(0, 0), (2, 0)]

/-- `reversible_heun_s_general_11` (advertised strong order 0.5): the step agrees with the Stratonovich (as Itô with drift f + ½ g g_y)–Taylor expansion in every grade ≤ 1;
    the remainder beyond grade 2 is an explicit polynomial. -/
theorem reversible_heun_s_general_11_taylor (F00 F01 G00 G01 G02 G10 t0 y0 s ξ : K) :
    Gen.reversible_heun_s_general_11_y1_0_0 (fun t y => F00 + F01 * (y - y0)) (fun t y => G00 + G01 * (y - y0) + G02 * (y - y0)^2 + G10 * (t - t0)) t0 (t0 + s^2) y0 (s * ξ) y0 F00 G00
      = y0 + s * T1 G00 ξ + s^2 * polyXZ (reversible_heun_s_general_11_Mc F00 F01 G00 G01 G02 G10) reversible_heun_s_general_11_supp ξ 0
        + s^3 * ((1/2) * G10 * ξ + (1/2) * F00 * F01 * s + (1/2) * F00 * G01 * ξ + (1/2) * F01 * G00 * ξ + F00 * G00 * G02 * s * ξ^2 + (1/2) * F00^2 * G02 * s^2 * ξ + (1/2) * G00^2 * G02 * ξ^3) := by
  simp only [Gen.reversible_heun_s_general_11_y1_0_0, T1, T2, T3, strat_a00, strat_a01, polyXZ, reversible_heun_s_general_11_Mc, reversible_heun_s_general_11_supp, List.map, List.sum_cons, List.sum_nil, add_sub_cancel_left]
  try (first | (field_simp; ring) | ring)

/-- `reversible_heun_s_general_11`: the mean of the grade-2 coefficient equals the mean of the Taylor expansion's (so the local mean error is O(h^1.5)) -/
theorem reversible_heun_s_general_11_mean (F00 F01 G00 G01 G02 G10 : K) :
    gaussE (reversible_heun_s_general_11_Mc F00 F01 G00 G01 G02 G10) reversible_heun_s_general_11_supp = (strat_a00 F00 G00 G01) := by
  simp only [gaussE, reversible_heun_s_general_11_Mc, reversible_heun_s_general_11_supp, List.map, List.sum_cons, List.sum_nil, moment, mean4, strat_a00, strat_a01]
  try (first | (field_simp; ring) | ring)

/-- `reversible_heun_s_scalar_11`: grade-2 coefficient of the step, as a polynomial in (ξ, ζ) -/
def reversible_heun_s_scalar_11_Mc (F00 F01 G00 G01 G02 G10 : K) : Nat → Nat → K
  | 0, 0 => F00
  | 2, 0 => (1/2) * G00 * G01
  | _, _ => 0
def reversible_heun_s_scalar_11_supp : List (Nat × Nat) := [(0, 0), (2, 0)]

/-- `reversible_heun_s_scalar_11` (advertised strong order 0.5): the step agrees with the Stratonovich (as Itô with drift f + ½ g g_y)–Taylor expansion in every grade ≤ 1;
    the remainder beyond grade 2 is an explicit polynomial. -/
theorem reversible_heun_s_scalar_11_taylor (F00 F01 G00 G01 G02 G10 t0 y0 s ξ : K) :
    Gen.reversible_heun_s_scalar_11_y1_0_0 (fun t y => F00 + F01 * (y - y0)) (fun t y => G00 + G01 * (y - y0) + G02 * (y - y0)^2 + G10 * (t - t0)) t0 (t0 + s^2) y0 (s * ξ) y0 F00 G00
      = y0 + s * T1 G00 ξ + s^2 * polyXZ (reversible_heun_s_scalar_11_Mc F00 F01 G00 G01 G02 G10) reversible_heun_s_scalar_11_supp ξ 0
        + s^3 * ((1/2) * G10 * ξ + (1/2) * F00 * F01 * s + (1/2) * F00 * G01 * ξ + (1/2) * F01 * G00 * ξ + F00 * G00 * G02 * s * ξ^2 + (1/2) * F00^2 * G02 * s^2 * ξ + (1/2) * G00^2 * G02 * ξ^3) := by
  simp only [Gen.reversible_heun_s_scalar_11_y1_0_0, T1, T2, T3, strat_a00, strat_a01, polyXZ, reversible_heun_s_scalar_11_Mc, reversible_heun_s_scalar_11_supp, List.map, List.sum_cons, List.sum_nil, add_sub_cancel_left]
  try (first | (field_simp; ring) | ring)

/-- `reversible_heun_s_scalar_11`: the mean of the grade-2 coefficient equals the mean of the Taylor expansion's (so the local mean error is O(h^1.5)) -/
theorem reversible_heun_s_scalar_11_mean (F00 F01 G00 G01 G02 G10 : K) :
    gaussE (reversible_heun_s_scalar_11_Mc F00 F01 G00 G01 G02 G10) reversible_heun_s_scalar_11_supp = (strat_a00 F00 G00 G01) := by
  simp only [gaussE, reversible_heun_s_scalar_11_Mc, reversible_heun_s_scalar_11_supp, List.map, List.sum_cons, List.sum_nil, moment, mean4, strat_a00, strat_a01]
  try (first | (field_simp; ring) | ring)

/-- `srk_i_additive_11`: grade-4 coefficient of the step, as a polynomial in (ξ, ζ) -/
def srk_i_additive_11_Mc (F00 F01 F02 F03 F10 F11 G00 G10 G20 : K) : Nat → Nat → K
  | 0, 0 => (1/2) * F10 + (1/2) * F00 * F01
  | 0, 2 => (3/2) * F02 * G00^2
  | _, _ => 0
def srk_i_additive_11_supp : List (Nat × Nat) := [(0, 0), (0, 2)]

/-- `srk_i_additive_11` (advertised strong order 1.5): the step agrees with the Itô–Taylor expansion in every grade ≤ 3;
    the remainder beyond grade 4 is an explicit polynomial. -/
theorem srk_i_additive_11_taylor (F00 F01 F02 F03 F10 F11 G00 G10 G20 t0 y0 s ξ ζ : K) (hs : s ≠ 0) :
    Gen.srk_i_additive_11_y1_0_0 (fun t y => F00 + F01 * (y - y0) + F02 * (y - y0)^2 + F03 * (y - y0)^3 + F10 * (t - t0) + F11 * (t - t0) * (y - y0)) (fun t => G00 + G10 * (t - t0) + G20 * (t - t0)^2) t0 (t0 + s^2) y0 (s * ξ) (s^3 * ζ)
      = y0 + s * T1 G00 ξ + s^2 * T2 F00 G00 0 ξ + s^3 * T3 F00 F01 G00 0 0 G10 ξ ζ + s^4 * polyXZ (srk_i_additive_11_Mc F00 F01 F02 F03 F10 F11 G00 G10 G20) srk_i_additive_11_supp ξ ζ
        + s^5 * ((-1) * G20 * ζ + G20 * ξ + (3/8) * F00 * F11 * s + F01 * G10 * ζ + (3/4) * F11 * G00 * ζ + (3/2) * F00 * F02 * G00 * ζ + (3/8) * F00^2 * F02 * s + F01 * G20 * s^2 * ζ + (3/4) * F11 * G10 * s^2 * ζ + (3/2) * F00 * F02 * G10 * s^2 * ζ + 3 * F02 * G00 * G10 * s * ζ^2 + (27/8) * F00 * F03 * G00^2 * s * ζ^2 + (27/16) * F00^2 * F03 * G00 * s^2 * ζ + (9/32) * F00^3 * F03 * s^3 + (9/4) * F03 * G00^3 * ζ^3 + (3/4) * F11 * G20 * s^4 * ζ + (3/2) * F00 * F02 * G20 * s^4 * ζ + 3 * F02 * G00 * G20 * s^3 * ζ^2 + (3/2) * F02 * G10^2 * s^3 * ζ^2 + (27/4) * F00 * F03 * G00 * G10 * s^3 * ζ^2 + (27/16) * F00^2 * F03 * G10 * s^4 * ζ + (27/4) * F03 * G00^2 * G10 * s^2 * ζ^3 + 3 * F02 * G10 * G20 * s^5 * ζ^2 + (27/4) * F00 * F03 * G00 * G20 * s^5 * ζ^2 + (27/8) * F00 * F03 * G10^2 * s^5 * ζ^2 + (27/16) * F00^2 * F03 * G20 * s^6 * ζ + (27/4) * F03 * G00 * G10^2 * s^4 * ζ^3 + (27/4) * F03 * G00^2 * G20 * s^4 * ζ^3 + (3/2) * F02 * G20^2 * s^7 * ζ^2 + (27/4) * F00 * F03 * G10 * G20 * s^7 * ζ^2 + (27/2) * F03 * G00 * G10 * G20 * s^6 * ζ^3 + (9/4) * F03 * G10^3 * s^6 * ζ^3 + (27/8) * F00 * F03 * G20^2 * s^9 * ζ^2 + (27/4) * F03 * G00 * G20^2 * s^8 * ζ^3 + (27/4) * F03 * G10^2 * G20 * s^8 * ζ^3 + (27/4) * F03 * G10 * G20^2 * s^10 * ζ^3 + (9/4) * F03 * G20^3 * s^12 * ζ^3) := by
  simp only [Gen.srk_i_additive_11_y1_0_0, T1, T2, T3, strat_a00, strat_a01, polyXZ, srk_i_additive_11_Mc, srk_i_additive_11_supp, List.map, List.sum_cons, List.sum_nil, add_sub_cancel_left]
  try (first | (field_simp; ring) | ring)

/-- `srk_i_additive_11`: the mean of the grade-4 coefficient equals the mean of the Taylor expansion's (so the local mean error is O(h^2.5)) -/
theorem srk_i_additive_11_mean (F00 F01 F02 F03 F10 F11 G00 G10 G20 : K) :
    gaussE (srk_i_additive_11_Mc F00 F01 F02 F03 F10 F11 G00 G10 G20) srk_i_additive_11_supp = mean4 F00 F01 F02 F10 G00 := by
  simp only [gaussE, srk_i_additive_11_Mc, srk_i_additive_11_supp, List.map, List.sum_cons, List.sum_nil, moment, mean4, strat_a00, strat_a01]
  try (first | (field_simp; ring) | ring)

end C02T
