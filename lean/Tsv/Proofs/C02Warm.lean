/-
C02 — a solver step is a function of its arguments: no memory of earlier steps on the same solver object.

WRITTEN BY vlib/author_c02warm.py; COMMITTED; re-checked against the regenerated lean/Tsv/Gen/Warm.lean and Steps.lean.
`Gen.<step>_warm_*` is the step traced AFTER a different step `[t0, (t0+t1)/2]` was taken (and discarded) on the SAME real solver object
(what adaptive stepping does). Theorems: it is the same expression as the step of a fresh solver (`rfl`-level), so the Taylor
theorems of C02Taylor / C02SRK apply to every step of a run, not only to the first one.
-/
import Tsv.Gen.Warm
import Tsv.Gen.Steps

namespace C02Warm
set_option linter.unusedVariables false
variable {K : Type} [Field K] [LinearOrder K]

theorem euler_i_diagonal_11_warm_eq  (f : K → K → K) (g : K → K → K) (t0 t1 y0_0_0 dW_0_0 : K) :
    Gen.euler_i_diagonal_11_warm_y1_0_0 f g t0 t1 y0_0_0 dW_0_0 = Gen.euler_i_diagonal_11_y1_0_0 f g t0 t1 y0_0_0 dW_0_0 := by
  rfl

theorem euler_i_additive_11_warm_eq  (f : K → K → K) (g : K → K) (t0 t1 y0_0_0 dW_0_0 : K) :
    Gen.euler_i_additive_11_warm_y1_0_0 f g t0 t1 y0_0_0 dW_0_0 = Gen.euler_i_additive_11_y1_0_0 f g t0 t1 y0_0_0 dW_0_0 := by
  rfl

theorem euler_i_scalar_11_warm_eq  (f : K → K → K) (g : K → K → K) (t0 t1 y0_0_0 dW_0_0 : K) :
    Gen.euler_i_scalar_11_warm_y1_0_0 f g t0 t1 y0_0_0 dW_0_0 = Gen.euler_i_scalar_11_y1_0_0 f g t0 t1 y0_0_0 dW_0_0 := by
  rfl

theorem euler_i_general_11_warm_eq  (f : K → K → K) (g : K → K → K) (t0 t1 y0_0_0 dW_0_0 : K) :
    Gen.euler_i_general_11_warm_y1_0_0 f g t0 t1 y0_0_0 dW_0_0 = Gen.euler_i_general_11_y1_0_0 f g t0 t1 y0_0_0 dW_0_0 := by
  rfl

theorem milstein_i_diagonal_11_warm_eq  (f : K → K → K) (g : K → K → K) (g_d1 : K → K → K) (t0 t1 y0_0_0 dW_0_0 : K) :
    Gen.milstein_i_diagonal_11_warm_y1_0_0 f g g_d1 t0 t1 y0_0_0 dW_0_0 = Gen.milstein_i_diagonal_11_y1_0_0 f g g_d1 t0 t1 y0_0_0 dW_0_0 := by
  rfl

theorem milstein_i_diagonal_11_gf_warm_eq (sqrt : K → K) (f : K → K → K) (g : K → K → K) (t0 t1 y0_0_0 dW_0_0 : K) :
    Gen.milstein_i_diagonal_11_gf_warm_y1_0_0 sqrt f g t0 t1 y0_0_0 dW_0_0 = Gen.milstein_i_diagonal_11_gf_y1_0_0 sqrt f g t0 t1 y0_0_0 dW_0_0 := by
  rfl

theorem milstein_i_additive_11_warm_eq  (f : K → K → K) (g : K → K) (t0 t1 y0_0_0 dW_0_0 : K) :
    Gen.milstein_i_additive_11_warm_y1_0_0 f g t0 t1 y0_0_0 dW_0_0 = Gen.milstein_i_additive_11_y1_0_0 f g t0 t1 y0_0_0 dW_0_0 := by
  rfl

theorem milstein_i_scalar_11_warm_eq  (f : K → K → K) (g : K → K → K) (g_d1 : K → K → K) (t0 t1 y0_0_0 dW_0_0 : K) :
    Gen.milstein_i_scalar_11_warm_y1_0_0 f g g_d1 t0 t1 y0_0_0 dW_0_0 = Gen.milstein_i_scalar_11_y1_0_0 f g g_d1 t0 t1 y0_0_0 dW_0_0 := by
  rfl

theorem milstein_i_scalar_11_gf_warm_eq (sqrt : K → K) (f : K → K → K) (g : K → K → K) (t0 t1 y0_0_0 dW_0_0 : K) :
    Gen.milstein_i_scalar_11_gf_warm_y1_0_0 sqrt f g t0 t1 y0_0_0 dW_0_0 = Gen.milstein_i_scalar_11_gf_y1_0_0 sqrt f g t0 t1 y0_0_0 dW_0_0 := by
  rfl

theorem milstein_s_diagonal_11_warm_eq  (f : K → K → K) (g : K → K → K) (g_d1 : K → K → K) (t0 t1 y0_0_0 dW_0_0 : K) :
    Gen.milstein_s_diagonal_11_warm_y1_0_0 f g g_d1 t0 t1 y0_0_0 dW_0_0 = Gen.milstein_s_diagonal_11_y1_0_0 f g g_d1 t0 t1 y0_0_0 dW_0_0 := by
  rfl

theorem milstein_s_diagonal_11_gf_warm_eq (sqrt : K → K) (f : K → K → K) (g : K → K → K) (t0 t1 y0_0_0 dW_0_0 : K) :
    Gen.milstein_s_diagonal_11_gf_warm_y1_0_0 sqrt f g t0 t1 y0_0_0 dW_0_0 = Gen.milstein_s_diagonal_11_gf_y1_0_0 sqrt f g t0 t1 y0_0_0 dW_0_0 := by
  rfl

theorem milstein_s_additive_11_warm_eq  (f : K → K → K) (g : K → K) (t0 t1 y0_0_0 dW_0_0 : K) :
    Gen.milstein_s_additive_11_warm_y1_0_0 f g t0 t1 y0_0_0 dW_0_0 = Gen.milstein_s_additive_11_y1_0_0 f g t0 t1 y0_0_0 dW_0_0 := by
  rfl

theorem milstein_s_scalar_11_warm_eq  (f : K → K → K) (g : K → K → K) (g_d1 : K → K → K) (t0 t1 y0_0_0 dW_0_0 : K) :
    Gen.milstein_s_scalar_11_warm_y1_0_0 f g g_d1 t0 t1 y0_0_0 dW_0_0 = Gen.milstein_s_scalar_11_y1_0_0 f g g_d1 t0 t1 y0_0_0 dW_0_0 := by
  rfl

theorem milstein_s_scalar_11_gf_warm_eq (sqrt : K → K) (f : K → K → K) (g : K → K → K) (t0 t1 y0_0_0 dW_0_0 : K) :
    Gen.milstein_s_scalar_11_gf_warm_y1_0_0 sqrt f g t0 t1 y0_0_0 dW_0_0 = Gen.milstein_s_scalar_11_gf_y1_0_0 sqrt f g t0 t1 y0_0_0 dW_0_0 := by
  rfl

theorem srk_i_diagonal_11_warm_eq (sqrt : K → K) (f : K → K → K) (g : K → K → K) (t0 t1 y0_0_0 dW_0_0 U_0_0 : K) :
    Gen.srk_i_diagonal_11_warm_y1_0_0 sqrt f g t0 t1 y0_0_0 dW_0_0 U_0_0 = Gen.srk_i_diagonal_11_y1_0_0 sqrt f g t0 t1 y0_0_0 dW_0_0 U_0_0 := by
  rfl

theorem srk_i_additive_11_warm_eq  (f : K → K → K) (g : K → K) (t0 t1 y0_0_0 dW_0_0 U_0_0 : K) :
    Gen.srk_i_additive_11_warm_y1_0_0 f g t0 t1 y0_0_0 dW_0_0 U_0_0 = Gen.srk_i_additive_11_y1_0_0 f g t0 t1 y0_0_0 dW_0_0 U_0_0 := by
  rfl

theorem srk_i_scalar_11_warm_eq (sqrt : K → K) (f : K → K → K) (g : K → K → K) (t0 t1 y0_0_0 dW_0_0 U_0_0 : K) :
    Gen.srk_i_scalar_11_warm_y1_0_0 sqrt f g t0 t1 y0_0_0 dW_0_0 U_0_0 = Gen.srk_i_scalar_11_y1_0_0 sqrt f g t0 t1 y0_0_0 dW_0_0 U_0_0 := by
  rfl

theorem euler_heun_s_diagonal_11_warm_eq  (f : K → K → K) (g : K → K → K) (t0 t1 y0_0_0 dW_0_0 : K) :
    Gen.euler_heun_s_diagonal_11_warm_y1_0_0 f g t0 t1 y0_0_0 dW_0_0 = Gen.euler_heun_s_diagonal_11_y1_0_0 f g t0 t1 y0_0_0 dW_0_0 := by
  rfl

theorem euler_heun_s_additive_11_warm_eq  (f : K → K → K) (g : K → K) (t0 t1 y0_0_0 dW_0_0 : K) :
    Gen.euler_heun_s_additive_11_warm_y1_0_0 f g t0 t1 y0_0_0 dW_0_0 = Gen.euler_heun_s_additive_11_y1_0_0 f g t0 t1 y0_0_0 dW_0_0 := by
  rfl

theorem euler_heun_s_scalar_11_warm_eq  (f : K → K → K) (g : K → K → K) (t0 t1 y0_0_0 dW_0_0 : K) :
    Gen.euler_heun_s_scalar_11_warm_y1_0_0 f g t0 t1 y0_0_0 dW_0_0 = Gen.euler_heun_s_scalar_11_y1_0_0 f g t0 t1 y0_0_0 dW_0_0 := by
  rfl

theorem euler_heun_s_general_11_warm_eq  (f : K → K → K) (g : K → K → K) (t0 t1 y0_0_0 dW_0_0 : K) :
    Gen.euler_heun_s_general_11_warm_y1_0_0 f g t0 t1 y0_0_0 dW_0_0 = Gen.euler_heun_s_general_11_y1_0_0 f g t0 t1 y0_0_0 dW_0_0 := by
  rfl

theorem heun_s_diagonal_11_warm_eq  (f : K → K → K) (g : K → K → K) (t0 t1 y0_0_0 dW_0_0 : K) :
    Gen.heun_s_diagonal_11_warm_y1_0_0 f g t0 t1 y0_0_0 dW_0_0 = Gen.heun_s_diagonal_11_y1_0_0 f g t0 t1 y0_0_0 dW_0_0 := by
  rfl

theorem heun_s_additive_11_warm_eq  (f : K → K → K) (g : K → K) (t0 t1 y0_0_0 dW_0_0 : K) :
    Gen.heun_s_additive_11_warm_y1_0_0 f g t0 t1 y0_0_0 dW_0_0 = Gen.heun_s_additive_11_y1_0_0 f g t0 t1 y0_0_0 dW_0_0 := by
  rfl

theorem heun_s_scalar_11_warm_eq  (f : K → K → K) (g : K → K → K) (t0 t1 y0_0_0 dW_0_0 : K) :
    Gen.heun_s_scalar_11_warm_y1_0_0 f g t0 t1 y0_0_0 dW_0_0 = Gen.heun_s_scalar_11_y1_0_0 f g t0 t1 y0_0_0 dW_0_0 := by
  rfl

theorem heun_s_general_11_warm_eq  (f : K → K → K) (g : K → K → K) (t0 t1 y0_0_0 dW_0_0 : K) :
    Gen.heun_s_general_11_warm_y1_0_0 f g t0 t1 y0_0_0 dW_0_0 = Gen.heun_s_general_11_y1_0_0 f g t0 t1 y0_0_0 dW_0_0 := by
  rfl

theorem midpoint_s_diagonal_11_warm_eq  (f : K → K → K) (g : K → K → K) (t0 t1 y0_0_0 dW_0_0 : K) :
    Gen.midpoint_s_diagonal_11_warm_y1_0_0 f g t0 t1 y0_0_0 dW_0_0 = Gen.midpoint_s_diagonal_11_y1_0_0 f g t0 t1 y0_0_0 dW_0_0 := by
  rfl

theorem midpoint_s_additive_11_warm_eq  (f : K → K → K) (g : K → K) (t0 t1 y0_0_0 dW_0_0 : K) :
    Gen.midpoint_s_additive_11_warm_y1_0_0 f g t0 t1 y0_0_0 dW_0_0 = Gen.midpoint_s_additive_11_y1_0_0 f g t0 t1 y0_0_0 dW_0_0 := by
  rfl

theorem midpoint_s_scalar_11_warm_eq  (f : K → K → K) (g : K → K → K) (t0 t1 y0_0_0 dW_0_0 : K) :
    Gen.midpoint_s_scalar_11_warm_y1_0_0 f g t0 t1 y0_0_0 dW_0_0 = Gen.midpoint_s_scalar_11_y1_0_0 f g t0 t1 y0_0_0 dW_0_0 := by
  rfl

theorem midpoint_s_general_11_warm_eq  (f : K → K → K) (g : K → K → K) (t0 t1 y0_0_0 dW_0_0 : K) :
    Gen.midpoint_s_general_11_warm_y1_0_0 f g t0 t1 y0_0_0 dW_0_0 = Gen.midpoint_s_general_11_y1_0_0 f g t0 t1 y0_0_0 dW_0_0 := by
  rfl

theorem log_ode_s_diagonal_11_warm_eq  (f : K → K → K) (g : K → K → K) (t0 t1 y0_0_0 dW_0_0 U_0_0 A_0_0_0 : K) :
    Gen.log_ode_s_diagonal_11_warm_y1_0_0 f g t0 t1 y0_0_0 dW_0_0 U_0_0 A_0_0_0 = Gen.log_ode_s_diagonal_11_y1_0_0 f g t0 t1 y0_0_0 dW_0_0 U_0_0 A_0_0_0 := by
  rfl

theorem log_ode_s_additive_11_warm_eq  (f : K → K → K) (g : K → K) (t0 t1 y0_0_0 dW_0_0 U_0_0 A_0_0_0 : K) :
    Gen.log_ode_s_additive_11_warm_y1_0_0 f g t0 t1 y0_0_0 dW_0_0 U_0_0 A_0_0_0 = Gen.log_ode_s_additive_11_y1_0_0 f g t0 t1 y0_0_0 dW_0_0 U_0_0 A_0_0_0 := by
  rfl

theorem log_ode_s_scalar_11_warm_eq  (f : K → K → K) (g : K → K → K) (t0 t1 y0_0_0 dW_0_0 U_0_0 A_0_0_0 : K) :
    Gen.log_ode_s_scalar_11_warm_y1_0_0 f g t0 t1 y0_0_0 dW_0_0 U_0_0 A_0_0_0 = Gen.log_ode_s_scalar_11_y1_0_0 f g t0 t1 y0_0_0 dW_0_0 U_0_0 A_0_0_0 := by
  rfl

theorem log_ode_s_general_11_warm_eq  (f : K → K → K) (g : K → K → K) (g_d1 : K → K → K) (t0 t1 y0_0_0 dW_0_0 U_0_0 A_0_0_0 : K) :
    Gen.log_ode_s_general_11_warm_y1_0_0 f g g_d1 t0 t1 y0_0_0 dW_0_0 U_0_0 A_0_0_0 = Gen.log_ode_s_general_11_y1_0_0 f g g_d1 t0 t1 y0_0_0 dW_0_0 U_0_0 A_0_0_0 := by
  rfl

theorem reversible_heun_s_diagonal_11_warm_eq  (f : K → K → K) (g : K → K → K) (t0 t1 y0_0_0 dW_0_0 z0_0_0 f0_0_0 g0_0_0 : K) :
    Gen.reversible_heun_s_diagonal_11_warm_y1_0_0 f g t0 t1 y0_0_0 dW_0_0 z0_0_0 f0_0_0 g0_0_0 = Gen.reversible_heun_s_diagonal_11_y1_0_0 f g t0 t1 y0_0_0 dW_0_0 z0_0_0 f0_0_0 g0_0_0 ∧
    Gen.reversible_heun_s_diagonal_11_warm_f1_0_0 f g t0 t1 y0_0_0 dW_0_0 z0_0_0 f0_0_0 g0_0_0 = Gen.reversible_heun_s_diagonal_11_f1_0_0 f g t0 t1 y0_0_0 dW_0_0 z0_0_0 f0_0_0 g0_0_0 ∧
    Gen.reversible_heun_s_diagonal_11_warm_g1_0_0 f g t0 t1 y0_0_0 dW_0_0 z0_0_0 f0_0_0 g0_0_0 = Gen.reversible_heun_s_diagonal_11_g1_0_0 f g t0 t1 y0_0_0 dW_0_0 z0_0_0 f0_0_0 g0_0_0 ∧
    Gen.reversible_heun_s_diagonal_11_warm_z1_0_0 f g t0 t1 y0_0_0 dW_0_0 z0_0_0 f0_0_0 g0_0_0 = Gen.reversible_heun_s_diagonal_11_z1_0_0 f g t0 t1 y0_0_0 dW_0_0 z0_0_0 f0_0_0 g0_0_0 := by
  refine ⟨?_, ?_, ?_, ?_⟩ <;> rfl

theorem reversible_heun_s_additive_11_warm_eq  (f : K → K → K) (g : K → K) (t0 t1 y0_0_0 dW_0_0 z0_0_0 f0_0_0 g0_0_0_0 : K) :
    Gen.reversible_heun_s_additive_11_warm_y1_0_0 f g t0 t1 y0_0_0 dW_0_0 z0_0_0 f0_0_0 g0_0_0_0 = Gen.reversible_heun_s_additive_11_y1_0_0 f g t0 t1 y0_0_0 dW_0_0 z0_0_0 f0_0_0 g0_0_0_0 ∧
    Gen.reversible_heun_s_additive_11_warm_f1_0_0 f g t0 t1 y0_0_0 dW_0_0 z0_0_0 f0_0_0 g0_0_0_0 = Gen.reversible_heun_s_additive_11_f1_0_0 f g t0 t1 y0_0_0 dW_0_0 z0_0_0 f0_0_0 g0_0_0_0 ∧
    Gen.reversible_heun_s_additive_11_warm_g1_0_0_0 f g t0 t1 y0_0_0 dW_0_0 z0_0_0 f0_0_0 g0_0_0_0 = Gen.reversible_heun_s_additive_11_g1_0_0_0 f g t0 t1 y0_0_0 dW_0_0 z0_0_0 f0_0_0 g0_0_0_0 ∧
    Gen.reversible_heun_s_additive_11_warm_z1_0_0 f g t0 t1 y0_0_0 dW_0_0 z0_0_0 f0_0_0 g0_0_0_0 = Gen.reversible_heun_s_additive_11_z1_0_0 f g t0 t1 y0_0_0 dW_0_0 z0_0_0 f0_0_0 g0_0_0_0 := by
  refine ⟨?_, ?_, ?_, ?_⟩ <;> rfl

theorem reversible_heun_s_scalar_11_warm_eq  (f : K → K → K) (g : K → K → K) (t0 t1 y0_0_0 dW_0_0 z0_0_0 f0_0_0 g0_0_0_0 : K) :
    Gen.reversible_heun_s_scalar_11_warm_y1_0_0 f g t0 t1 y0_0_0 dW_0_0 z0_0_0 f0_0_0 g0_0_0_0 = Gen.reversible_heun_s_scalar_11_y1_0_0 f g t0 t1 y0_0_0 dW_0_0 z0_0_0 f0_0_0 g0_0_0_0 ∧
    Gen.reversible_heun_s_scalar_11_warm_f1_0_0 f g t0 t1 y0_0_0 dW_0_0 z0_0_0 f0_0_0 g0_0_0_0 = Gen.reversible_heun_s_scalar_11_f1_0_0 f g t0 t1 y0_0_0 dW_0_0 z0_0_0 f0_0_0 g0_0_0_0 ∧
    Gen.reversible_heun_s_scalar_11_warm_g1_0_0_0 f g t0 t1 y0_0_0 dW_0_0 z0_0_0 f0_0_0 g0_0_0_0 = Gen.reversible_heun_s_scalar_11_g1_0_0_0 f g t0 t1 y0_0_0 dW_0_0 z0_0_0 f0_0_0 g0_0_0_0 ∧
    Gen.reversible_heun_s_scalar_11_warm_z1_0_0 f g t0 t1 y0_0_0 dW_0_0 z0_0_0 f0_0_0 g0_0_0_0 = Gen.reversible_heun_s_scalar_11_z1_0_0 f g t0 t1 y0_0_0 dW_0_0 z0_0_0 f0_0_0 g0_0_0_0 := by
  refine ⟨?_, ?_, ?_, ?_⟩ <;> rfl

theorem reversible_heun_s_general_11_warm_eq  (f : K → K → K) (g : K → K → K) (t0 t1 y0_0_0 dW_0_0 z0_0_0 f0_0_0 g0_0_0_0 : K) :
    Gen.reversible_heun_s_general_11_warm_y1_0_0 f g t0 t1 y0_0_0 dW_0_0 z0_0_0 f0_0_0 g0_0_0_0 = Gen.reversible_heun_s_general_11_y1_0_0 f g t0 t1 y0_0_0 dW_0_0 z0_0_0 f0_0_0 g0_0_0_0 ∧
    Gen.reversible_heun_s_general_11_warm_f1_0_0 f g t0 t1 y0_0_0 dW_0_0 z0_0_0 f0_0_0 g0_0_0_0 = Gen.reversible_heun_s_general_11_f1_0_0 f g t0 t1 y0_0_0 dW_0_0 z0_0_0 f0_0_0 g0_0_0_0 ∧
    Gen.reversible_heun_s_general_11_warm_g1_0_0_0 f g t0 t1 y0_0_0 dW_0_0 z0_0_0 f0_0_0 g0_0_0_0 = Gen.reversible_heun_s_general_11_g1_0_0_0 f g t0 t1 y0_0_0 dW_0_0 z0_0_0 f0_0_0 g0_0_0_0 ∧
    Gen.reversible_heun_s_general_11_warm_z1_0_0 f g t0 t1 y0_0_0 dW_0_0 z0_0_0 f0_0_0 g0_0_0_0 = Gen.reversible_heun_s_general_11_z1_0_0 f g t0 t1 y0_0_0 dW_0_0 z0_0_0 f0_0_0 g0_0_0_0 := by
  refine ⟨?_, ?_, ?_, ?_⟩ <;> rfl

end C02Warm
