/-
C19 — unsupported combinations and malformed inputs are rejected up-front.

Every theorem is about `Model.Dispatch` (the hand-written composition) instantiated with `Gen.Tables.tables`, the primitive
facts regenerated from the current torchsde sources on every run; `Spec` is the documented support matrix.
The finite statements are decided by evaluation in the kernel over the WHOLE product, no sampling: 3520 forward
configurations; the backward pass depends on the forward call only through (sde type, noise type, method and Levy area after
check_contract), so the adjoint statements are decided over those 6336 cases and then lifted to all 77440 adjoint
configurations by ordinary proofs.
-/
import Tsv.Model.Dispatch
import Tsv.Gen.Tables
import Tsv.Spec.Documented

namespace C19
open Model.Dispatch

abbrev T : Tables := Gen.Tables.tables

/-! ### the hand-written constructor model agrees with every direct construction of every solver class -/

theorem ctor_model_agrees : ∀ (cls : SolverClass) (st : SdeType) (nt : Noise) (lv : Levy) (isAdj gf : Bool),
    ctorModel T cls st nt lv isAdj gf = T.ctorProbe cls st nt lv isAdj gf := by decide +kernel

-- non-vacuity: the probes contain constructions that succeed and constructions that are refused
example : T.ctorProbe .SRK .ito .diagonal .spaceTime false false = .ok := by decide +kernel
example : T.ctorProbe .SRK .ito .general .spaceTime false false = .valueError := by decide +kernel
example : T.ctorProbe .SRK .ito .diagonal .spaceTime true false = .valueError := by decide +kernel

/-! ### forward: exactly the documented combinations integrate -/

theorem forward_matrix_cases : ∀ st nt m gf bm ad lq,
    forwardOutcome T ⟨st, nt, m, gf, bm, ad, lq⟩ = .integrates ↔ Spec.documented ⟨st, nt, m, gf, bm, ad, lq⟩ = true := by
  decide +kernel

theorem forward_matrix (c : Config) : forwardOutcome T c = .integrates ↔ Spec.documented c = true :=
  forward_matrix_cases c.st c.nt c.method c.gradFree c.bm c.adaptive c.logqp

example : forwardOutcome T ⟨.ito, .diagonal, .known .srk, false, .given .spaceTime, false, false⟩ = .integrates := by
  decide +kernel
example : forwardOutcome T ⟨.ito, .general, .known .srk, false, .absent, false, false⟩ = .error .valueError .noiseType := by
  decide +kernel
example : forwardOutcome T ⟨.ito, .diagonal, .known .srk, false, .given .noArea, false, false⟩ = .error .valueError .levy := by
  decide +kernel
example : forwardOutcome T ⟨.stratonovich, .general, .known .logOde, false, .absent, true, true⟩ = .integrates := by
  decide +kernel

theorem rejected_is_value_error_cases : ∀ st nt m gf bm ad lq,
    forwardOutcome T ⟨st, nt, m, gf, bm, ad, lq⟩ ≠ .integrates →
    ∃ s : Stage, forwardOutcome T ⟨st, nt, m, gf, bm, ad, lq⟩ = .error .valueError s ∧ s.upFront = true := by
  decide +kernel

/-- every other forward combination raises ValueError at a stage that precedes the first solver step -/
theorem rejected_is_value_error (c : Config) (h : forwardOutcome T c ≠ .integrates) :
    ∃ s : Stage, forwardOutcome T c = .error .valueError s ∧ s.upFront = true :=
  rejected_is_value_error_cases c.st c.nt c.method c.gradFree c.bm c.adaptive c.logqp h

-- non-vacuity: rejected configurations exist, at the different stages
example : forwardOutcome T ⟨.ito, .diagonal, .unknown, false, .absent, false, false⟩ = .error .valueError .contractMethod := by
  decide +kernel
example : forwardOutcome T ⟨.ito, .diagonal, .known .heun, false, .absent, false, false⟩ = .error .valueError .sdeType := by
  decide +kernel
example : forwardOutcome T ⟨.stratonovich, .diagonal, .known .adjointReversibleHeun, false, .absent, false, false⟩ =
    .error .valueError .adjointGuard := by decide +kernel

/-! ### defaults -/

theorem default_methods : ∀ (st : SdeType) (nt : Noise), T.defaultMethod st nt = Spec.defaultMethod st nt := by
  decide +kernel

theorem default_adjoint_methods : ∀ (st : SdeType) (nt : Noise) (m : Method),
    T.defaultAdjoint st nt m = Spec.defaultAdjoint st nt m := by
  decide +kernel

theorem default_method_used_cases : ∀ st nt gf bm ad lq,
    forwardOutcome T ⟨st, nt, .default, gf, bm, ad, lq⟩ =
      forwardOutcome T ⟨st, nt, .known (Spec.defaultMethod st nt), gf, bm, ad, lq⟩ := by
  decide +kernel

/-- `method=None` behaves exactly like passing the documented default explicitly -/
theorem default_method_used (c : Config) (h : c.method = .default) :
    forwardOutcome T c = forwardOutcome T { c with method := .known (Spec.defaultMethod c.st c.nt) } := by
  obtain ⟨st, nt, m, gf, bm, ad, lq⟩ := c
  cases h
  exact default_method_used_cases st nt gf bm ad lq

/-- with no method and no Brownian motion given, every SDE type / noise type integrates -/
theorem defaults_integrate : ∀ st nt gf ad lq, forwardOutcome T ⟨st, nt, .default, gf, .absent, ad, lq⟩ = .integrates := by
  decide +kernel

example : T.defaultMethod .ito .general = .euler ∧ T.defaultMethod .ito .scalar = .srk ∧
    T.defaultMethod .stratonovich .general = .midpoint := by decide +kernel

/-! ### adjoint: decided on the reduced product -/

/-- after a documented forward solve with method `m` and any Levy area, the backward pass integrates exactly for the
    documented adjoint methods -/
theorem backward_matrix : ∀ st nt m lv am agf, Spec.solverFor st m = true → Spec.noiseOk m nt = true →
    (backwardCore T ⟨st, nt, .known m, lv, am, agf⟩ = .integrates ↔ Spec.adjointSupported st nt m am agf = true) := by
  decide +kernel

/-- … and otherwise ends in an error; that error is raised before the first adjoint step is entered, except for Milstein
    on the adjoint of a scalar-noise SDE, which fails with NotImplementedError inside its first step -/
theorem backward_refusal : ∀ st nt m lv am agf, Spec.solverFor st m = true → Spec.noiseOk m nt = true →
    Spec.adjointSupported st nt m am agf = false →
    (backwardCore T ⟨st, nt, .known m, lv, am, agf⟩).isError = true ∧
    ((backwardCore T ⟨st, nt, .known m, lv, am, agf⟩).upFrontError = true ∨
      (backwardCore T ⟨st, nt, .known m, lv, am, agf⟩ = .error .notImplementedError .firstStep ∧ nt = .scalar ∧
        Bwd.adjMethod T ⟨st, nt, .known m, lv, am, agf⟩ = .known .milstein)) := by
  decide +kernel

/-- a documented forward call reaches the solver with the documented method -/
theorem documented_method_cases : ∀ st nt m gf bm ad lq, Spec.documented ⟨st, nt, m, gf, bm, ad, lq⟩ = true →
    effMethod T ⟨st, nt, m, gf, bm, ad, lq⟩ = .known (Spec.specMethod ⟨st, nt, m, gf, bm, ad, lq⟩) ∧
    Spec.solverFor st (Spec.specMethod ⟨st, nt, m, gf, bm, ad, lq⟩) = true ∧
    Spec.noiseOk (Spec.specMethod ⟨st, nt, m, gf, bm, ad, lq⟩) nt = true := by
  decide +kernel

/-! ### adjoint: lifted to every `sdeint_adjoint` call of the product -/

theorem adjointOutcome_backward (a : AdjConfig) (o : Outcome) :
    adjointOutcome T a = (.backward, o) ↔ forwardOutcome T a.fwd = .integrates ∧ backwardOutcome T a = o := by
  unfold adjointOutcome
  cases h : forwardOutcome T a.fwd with
  | integrates => simp
  | error e s => simp

theorem backward_eq (a : AdjConfig) (h : Spec.documented a.fwd = true) :
    backwardOutcome T a =
      backwardCore T ⟨a.fwd.st, a.fwd.nt, .known (Spec.specMethod a.fwd), effLevy T a.fwd, a.adjMethod, a.adjGradFree⟩ := by
  obtain ⟨⟨st, nt, m, gf, bm, ad, lq⟩, am, agf⟩ := a
  have := (documented_method_cases st nt m gf bm ad lq h).1
  simp only [backwardOutcome, resolveAdj, this]

/-- `sdeint_adjoint(...).backward()` integrates forward and backward exactly for the documented combinations -/
theorem adjoint_matrix (a : AdjConfig) :
    adjointOutcome T a = (.backward, .integrates) ↔ Spec.documentedAdjoint a = true := by
  rw [adjointOutcome_backward, forward_matrix]
  unfold Spec.documentedAdjoint
  rw [Bool.and_eq_true]
  constructor
  · rintro ⟨hd, hb⟩
    obtain ⟨_, h1, h2⟩ := documented_method_cases _ _ _ _ _ _ _ hd
    rw [backward_eq a hd] at hb
    exact ⟨hd, (backward_matrix _ _ _ _ _ _ h1 h2).mp hb⟩
  · rintro ⟨hd, hs⟩
    obtain ⟨_, h1, h2⟩ := documented_method_cases _ _ _ _ _ _ _ hd
    refine ⟨hd, ?_⟩
    rw [backward_eq a hd]
    exact (backward_matrix _ _ _ _ _ _ h1 h2).mpr hs

/-- an unsupported adjoint method after a supported forward solve: the forward pass runs and the backward pass ends in an
    error — nothing unsupported is integrated — and the error comes before the first adjoint step is entered, except in
    the one listed case (NotImplementedError inside the first step, no step completes) -/
theorem adjoint_unsupported_refused (a : AdjConfig) (hd : Spec.documented a.fwd = true)
    (hn : Spec.documentedAdjoint a = false) :
    ∃ o : Outcome, adjointOutcome T a = (.backward, o) ∧ o.isError = true ∧
      (o.upFrontError = true ∨ (o = .error .notImplementedError .firstStep ∧ a.fwd.nt = .scalar)) := by
  obtain ⟨_, h1, h2⟩ := documented_method_cases _ _ _ _ _ _ _ hd
  have hs : Spec.adjointSupported a.fwd.st a.fwd.nt (Spec.specMethod a.fwd) a.adjMethod a.adjGradFree = false := by
    unfold Spec.documentedAdjoint at hn
    rw [hd, Bool.true_and] at hn
    exact hn
  have := backward_refusal _ _ _ (effLevy T a.fwd) _ _ h1 h2 hs
  refine ⟨backwardOutcome T a, (adjointOutcome_backward a _).mpr ⟨(forward_matrix _).mpr hd, rfl⟩, ?_⟩
  rw [backward_eq a hd]
  refine ⟨this.1, this.2.imp id ?_⟩
  rintro ⟨h, hnt, _⟩
  exact ⟨h, hnt⟩

/-- the forward half of sdeint_adjoint is the forward matrix: an undocumented forward call never reaches the backward pass -/
theorem adjoint_forward_phase (a : AdjConfig) (h : Spec.documented a.fwd = false) :
    adjointOutcome T a = (.forward, forwardOutcome T a.fwd) ∧
      ∃ s : Stage, forwardOutcome T a.fwd = .error .valueError s ∧ s.upFront = true := by
  have hne : forwardOutcome T a.fwd ≠ .integrates := by
    intro hi
    rw [(forward_matrix _).mp hi] at h
    cases h
  refine ⟨?_, rejected_is_value_error _ hne⟩
  unfold adjointOutcome
  cases hf : forwardOutcome T a.fwd with
  | integrates => exact absurd hf hne
  | error e s => rfl

/-- with every default (no method, no adjoint method, no bm) the backward pass integrates -/
theorem adjoint_defaults_integrate : ∀ st nt gf ad lq,
    adjointOutcome T ⟨⟨st, nt, .default, gf, .absent, ad, lq⟩, .default, false⟩ = (.backward, .integrates) := by
  decide +kernel

example : adjointOutcome T ⟨⟨.stratonovich, .general, .known .reversibleHeun, false, .absent, false, false⟩,
    .known .adjointReversibleHeun, false⟩ = (.backward, .integrates) := by decide +kernel
example : adjointOutcome T ⟨⟨.stratonovich, .general, .known .midpoint, false, .absent, false, false⟩,
    .known .adjointReversibleHeun, false⟩ = (.backward, .error .runtimeError .initExtra) := by decide +kernel
example : adjointOutcome T ⟨⟨.ito, .diagonal, .default, false, .absent, false, false⟩, .known .srk, false⟩ =
    (.backward, .error .valueError .adjointGuard) := by decide +kernel
example : adjointOutcome T ⟨⟨.ito, .additive, .default, false, .absent, false, false⟩, .known .milstein, false⟩ =
    (.backward, .error .valueError .noiseType) := by decide +kernel
example : adjointOutcome T ⟨⟨.ito, .scalar, .default, false, .absent, false, false⟩, .known .milstein, false⟩ =
    (.backward, .error .notImplementedError .firstStep) := by decide +kernel
example : adjointOutcome T ⟨⟨.ito, .scalar, .default, false, .absent, false, false⟩, .unknown, false⟩ =
    (.backward, .error .valueError .select) := by decide +kernel
-- the hypotheses of adjoint_unsupported_refused are satisfiable
example : Spec.documented ⟨.ito, .scalar, .default, false, .absent, false, false⟩ = true ∧
    Spec.documentedAdjoint ⟨⟨.ito, .scalar, .default, false, .absent, false, false⟩, .known .srk, false⟩ = false := by
  decide +kernel

/-! ### malformed arguments: the validation sequence of check_contract (+ assert_no_grad) -/

theorem firstFail_some : ∀ {l : List (Bool × ErrClass × Check)} {e c}, firstFail l = some (e, c) → (true, e, c) ∈ l
  | [], _, _, h => by simp [firstFail] at h
  | (b, e', c') :: rest, e, c, h => by
    cases b with
    | true =>
      simp only [firstFail, if_true, Option.some.injEq, Prod.mk.injEq] at h
      obtain ⟨rfl, rfl⟩ := h
      exact List.mem_cons_self
    | false =>
      simp only [firstFail, Bool.false_eq_true, if_false] at h
      exact List.mem_cons_of_mem _ (firstFail_some h)

theorem firstFail_none : ∀ {l : List (Bool × ErrClass × Check)}, firstFail l = none → ∀ x ∈ l, x.1 = false
  | [], _, x, hx => by simp at hx
  | (b, e', c') :: rest, h, x, hx => by
    cases b with
    | true => simp [firstFail] at h
    | false =>
      simp only [firstFail, Bool.false_eq_true, if_false] at h
      rcases List.mem_cons.mp hx with rfl | hx
      · rfl
      · exact firstFail_none h x hx

theorem bmSizes_ok {s bb bn} (h : bmSizes s = .ok (bb, bn)) :
    (s = none ∧ bb = [] ∧ bn = []) ∨ ∃ b m, s = some [b, m] ∧ bb = [b] ∧ bn = [m] := by
  unfold bmSizes at h
  split at h
  · simp_all
  · simp only [Except.ok.injEq, Prod.mk.injEq] at h
    obtain ⟨rfl, rfl⟩ := h
    exact Or.inr ⟨_, _, rfl, rfl, rfl⟩
  · cases h

theorem driftSizes_ok {s fb fd} (h : driftSizes s = .ok (fb, fd)) :
    (s = none ∧ fb = [] ∧ fd = []) ∨ ∃ b d, s = some [b, d] ∧ fb = [b] ∧ fd = [d] := by
  unfold driftSizes at h
  split at h
  · simp_all
  · simp only [Except.ok.injEq, Prod.mk.injEq] at h
    obtain ⟨rfl, rfl⟩ := h
    exact Or.inr ⟨_, _, rfl, rfl, rfl⟩
  · cases h

theorem diffusionSizes_ok {dg s gb gd gn} (h : diffusionSizes dg s = .ok (gb, gd, gn)) :
    (s = none ∧ gb = [] ∧ gd = [] ∧ gn = []) ∨
    (dg = true ∧ ∃ b d, s = some [b, d] ∧ gb = [b] ∧ gd = [d] ∧ gn = [d]) ∨
    (dg = false ∧ ∃ b d m, s = some [b, d, m] ∧ gb = [b] ∧ gd = [d] ∧ gn = [m]) := by
  unfold diffusionSizes at h
  split at h
  · simp_all
  · split at h
    · rename_i hd
      split at h
      · simp only [Except.ok.injEq, Prod.mk.injEq] at h
        obtain ⟨rfl, rfl, rfl⟩ := h
        exact Or.inr (Or.inl ⟨hd, _, _, rfl, rfl, rfl, rfl⟩)
      · cases h
    · rename_i hd
      split at h
      · simp only [Except.ok.injEq, Prod.mk.injEq] at h
        obtain ⟨rfl, rfl, rfl⟩ := h
        exact Or.inr (Or.inr ⟨by simpa using hd, _, _, _, rfl, rfl, rfl, rfl⟩)
      · cases h

theorem allEq_cons {x : Nat} {xs : List Nat} : allEq (x :: xs) = true ↔ ∀ y ∈ xs, y = x := by
  simp [allEq]

/-- the shapes of a call fit together: y0 (b,d), drift (b,d), diffusion (b,d) resp. (b,d,m), bm (b,m) if given,
    one channel for scalar noise -/
def ShapesFit (a : CallArgs) : Prop :=
  ∃ b d m, a.y0Shape = [b, d] ∧ a.fShape = some [b, d] ∧
    ((a.noise = .diagonal ∧ m = d ∧ a.gShape = some [b, d]) ∨ (a.noise ≠ .diagonal ∧ a.gShape = some [b, d, m])) ∧
    (a.bmShape = none ∨ a.bmShape = some [b, m]) ∧ (a.noise = .scalar → m = 1)

/-- what acceptance means when `logqp` is off: no flag check fails, all shapes fit, nothing requires grad -/
theorem accepted_wellformed (a : CallArgs) (hl : a.logqp = false) (h : validate a = .accepted) :
    (∀ x ∈ flagChecks a, x.1 = false) ∧ ShapesFit a ∧ a.tsGrad = false ∧ a.dtGrad = false := by
  unfold validate at h
  split at h
  · cases h
  · rename_i hflags
    refine ⟨firstFail_none hflags, ?_⟩
    simp only [seenShapes, hl, Bool.false_eq_true, if_false] at h
    split at h
    · cases h
    · rename_i bs ds ms hcol
      split at h
      · cases h
      · rename_i hsz
        have hs := firstFail_none hsz
        simp only [sizeChecks, List.mem_cons, List.mem_nil_iff, or_false, forall_eq_or_imp, forall_eq] at hs
        obtain ⟨hf, hg, hb, hd, hm, hsc, hgr⟩ := hs
        have hb' : allEq bs = true := by simpa using hb
        have hd' : allEq ds = true := by simpa using hd
        have hm' : allEq ms = true := by simpa using hm
        have hgr' : a.tsGrad = false ∧ a.dtGrad = false := by simpa using hgr
        refine ⟨?_, hgr'⟩
        unfold collect at hcol
        split at hcol
        · rename_i b0 d0 hy0
          split at hcol
          · cases hcol
          · rename_i bb bn hbm
            split at hcol
            · cases hcol
            · rename_i fb fd hdr
              split at hcol
              · cases hcol
              · rename_i gb gd gn hdf
                simp only [Except.ok.injEq, Prod.mk.injEq] at hcol
                obtain ⟨rfl, rfl, rfl⟩ := hcol
                rcases driftSizes_ok hdr with ⟨hfn, _, _⟩ | ⟨b1, d1, hfs, rfl, rfl⟩
                · rw [hfn] at hf; simp at hf
                rcases diffusionSizes_ok hdf with ⟨hgn, _⟩ | ⟨hdiag, b2, d2, hgs, rfl, rfl, rfl⟩ |
                  ⟨hnd, b2, d2, m2, hgs, rfl, rfl, rfl⟩
                · rw [hgn] at hg; simp at hg
                · -- diagonal noise
                  have hnz : a.noise = .diagonal := by simpa using hdiag
                  rw [allEq_cons] at hb' hd'
                  have e1 : b1 = b0 := hb' b1 (by simp)
                  have e2 : b2 = b0 := hb' b2 (by simp)
                  have e3 : d1 = d0 := hd' d1 (by simp)
                  have e4 : d2 = d0 := hd' d2 (by simp)
                  refine ⟨b0, d0, d0, hy0, by rw [hfs, e1, e3], Or.inl ⟨hnz, rfl, by rw [hgs, e2, e4]⟩, ?_, ?_⟩
                  · rcases bmSizes_ok hbm with ⟨hn, _, _⟩ | ⟨b, m, hs, rfl, rfl⟩
                    · exact Or.inl hn
                    · have e5 : b = b0 := hb' b (by simp)
                      have e6 : d2 = m := (allEq_cons (x := m) (xs := [d2])).mp (by simpa using hm') d2 (by simp)
                      exact Or.inr (by rw [hs, e5, ← e6, e4])
                  · intro hsn; rw [hnz] at hsn; cases hsn
                · -- any other noise type
                  have hnz : a.noise ≠ .diagonal := by simpa using hnd
                  rw [allEq_cons] at hb' hd'
                  have e1 : b1 = b0 := hb' b1 (by simp)
                  have e2 : b2 = b0 := hb' b2 (by simp)
                  have e3 : d1 = d0 := hd' d1 (by simp)
                  have e4 : d2 = d0 := hd' d2 (by simp)
                  rcases bmSizes_ok hbm with ⟨hn, _, rfl⟩ | ⟨b, m, hs, rfl, rfl⟩
                  · refine ⟨b0, d0, m2, hy0, by rw [hfs, e1, e3], Or.inr ⟨hnz, by rw [hgs, e2, e4]⟩, Or.inl hn, ?_⟩
                    intro hsn
                    simpa [hsn] using hsc
                  · have e5 : b = b0 := hb' b (by simp)
                    have e6 : m2 = m := (allEq_cons (x := m) (xs := [m2])).mp (by simpa using hm') m2 (by simp)
                    refine ⟨b0, d0, m2, hy0, by rw [hfs, e1, e3], Or.inr ⟨hnz, by rw [hgs, e2, e4]⟩,
                      Or.inr (by rw [hs, e5, e6]), ?_⟩
                    intro hsn
                    have : m = 1 := by simpa [hsn] using hsc
                    rw [e6, this]
        · cases hcol

/-- a call is rejected with ValueError (at whatever check comes first) -/
def RejectedVE (a : CallArgs) : Prop := ∃ c, validate a = .rejected .valueError c

/-- error classes of the validation sequence: every rejection the model describes is a ValueError (since the fix recorded in
    known_findings.json, `logqp=True` on an SDE lacking `f`, `g` or `h` raises ValueError too; it was AttributeError) -/
theorem verdict_error_class (a : CallArgs) {e : ErrClass} {c : Check} (h : validate a = .rejected e c) :
    e = .valueError := by
  unfold validate at h
  split at h
  · rename_i e' c' hff
    simp only [Verdict.rejected.injEq] at h
    obtain ⟨rfl, rfl⟩ := h
    have hm := firstFail_some hff
    simp only [flagChecks, List.mem_cons, List.mem_nil_iff, or_false, Prod.mk.injEq] at hm
    rcases hm with ⟨_, rfl, _⟩ | ⟨_, rfl, _⟩ | ⟨_, rfl, _⟩ | ⟨_, rfl, _⟩ | ⟨_, rfl, _⟩ | ⟨_, rfl, _⟩ | ⟨_, rfl, _⟩ |
      ⟨_, rfl, _⟩ | ⟨_, rfl, _⟩ | ⟨_, rfl, _⟩
    all_goals rfl
  · split at h
    · cases h
    · split at h
      · simp only [Verdict.rejected.injEq] at h
        exact h.1.symm
      · split at h
        · rename_i e' c' hff
          simp only [Verdict.rejected.injEq] at h
          obtain ⟨rfl, rfl⟩ := h
          have hm := firstFail_some hff
          simp only [sizeChecks, List.mem_cons, List.mem_nil_iff, or_false, Prod.mk.injEq] at hm
          rcases hm with ⟨_, rfl, _⟩ | ⟨_, rfl, _⟩ | ⟨_, rfl, _⟩ | ⟨_, rfl, _⟩ | ⟨_, rfl, _⟩ | ⟨_, rfl, _⟩ | ⟨_, rfl, _⟩
          all_goals rfl
        · cases h

/-- without `logqp` the sequence has exactly two verdicts: accepted, or ValueError -/
theorem verdict_classes (a : CallArgs) (hl : a.logqp = false) : validate a = .accepted ∨ RejectedVE a := by
  cases hv : validate a with
  | accepted => exact Or.inl rfl
  | rejected e c =>
    have := verdict_error_class a hv
    subst this
    exact Or.inr ⟨c, hv⟩
  | unmodelled =>
    exfalso
    unfold validate at hv
    split at hv
    · cases hv
    · simp only [seenShapes, hl, Bool.false_eq_true, if_false] at hv
      split at hv
      · cases hv
      · split at hv <;> cases hv

/-- with `logqp` off, anything that is not well-formed is rejected with ValueError -/
theorem malformed_rejected (a : CallArgs) (hl : a.logqp = false)
    (h : (∃ x ∈ flagChecks a, x.1 = true) ∨ ¬ ShapesFit a ∨ a.tsGrad = true ∨ a.dtGrad = true) : RejectedVE a := by
  rcases verdict_classes a hl with hacc | hr
  · exfalso
    obtain ⟨h1, h2, h3, h4⟩ := accepted_wellformed a hl hacc
    rcases h with ⟨x, hx, hb⟩ | h | h | h
    · rw [h1 x hx] at hb; cases hb
    · exact h h2
    · rw [h3] at h; cases h
    · rw [h4] at h; cases h
  · exact hr

/-! #### one theorem per malformed class of the property -/

/-- the first failing flag check is a ValueError unless it is the logqp attribute check -/
theorem flag_rejected (a : CallArgs) {x : Bool × ErrClass × Check} (hx : x ∈ flagChecks a) (hb : x.1 = true)
    (_hattr : a.logqp = true → (a.fShape.isSome && a.gShape.isSome && a.hasH) = true) : RejectedVE a := by
  cases hff : firstFail (flagChecks a) with
  | none => have := firstFail_none hff x hx; rw [hb] at this; cases this
  | some ec =>
    obtain ⟨e, c⟩ := ec
    have hv : validate a = .rejected e c := by unfold validate; rw [hff]
    have := verdict_error_class a hv
    subst this
    exact ⟨c, hv⟩

/-- ts not strictly increasing (the SDE itself being usable: with logqp it has f, g and h) -/
theorem malformed_ts_order (a : CallArgs) (h : a.tsIncreasing = false)
    (hattr : a.logqp = true → (a.fShape.isSome && a.gShape.isSome && a.hasH) = true) : RejectedVE a :=
  flag_rejected a (x := (!a.tsIncreasing, .valueError, .tsOrder)) (by simp [flagChecks]) (by simp [h]) hattr

/-- y0 not 2-D: checked before anything else can go wrong differently, so no side condition at all -/
theorem malformed_y0_dim (a : CallArgs) (h : a.y0Shape.length ≠ 2) : RejectedVE a := by
  have key : ∃ c, firstFail (flagChecks a) = some (.valueError, c) := by
    simp only [flagChecks, firstFail]
    repeat' split
    all_goals first
      | exact ⟨_, rfl⟩
      | (exfalso; simp_all)
  obtain ⟨c, hc⟩ := key
  exact ⟨c, by unfold validate; rw [hc]⟩

theorem malformed_y0_not_tensor (a : CallArgs) (h : a.y0Tensor = false) : RejectedVE a := by
  have key : ∃ c, firstFail (flagChecks a) = some (.valueError, c) := by
    simp only [flagChecks, firstFail]
    repeat' split
    all_goals first
      | exact ⟨_, rfl⟩
      | (exfalso; simp_all)
  obtain ⟨c, hc⟩ := key
  exact ⟨c, by unfold validate; rw [hc]⟩

/-- inconsistent batch sizes (y0 vs drift / diffusion / bm) -/
theorem malformed_batch_partial (a : CallArgs) (hl : a.logqp = false) {b0 d0 : Nat} (hy : a.y0Shape = [b0, d0])
    (h : (∃ b d, a.fShape = some [b, d] ∧ b ≠ b0) ∨ (∃ b r, a.gShape = some (b :: r) ∧ b ≠ b0) ∨
      (∃ b m, a.bmShape = some [b, m] ∧ b ≠ b0)) : RejectedVE a := by
  refine malformed_rejected a hl (Or.inr (Or.inl ?_))
  rintro ⟨b, d, m, h1, h2, h3, h4, _⟩
  rw [hy] at h1
  simp only [List.cons.injEq, and_true] at h1
  obtain ⟨rfl, rfl⟩ := h1
  rcases h with ⟨b', d', hf, hne⟩ | ⟨b', r, hg, hne⟩ | ⟨b', m', hb, hne⟩
  · rw [h2] at hf; simp at hf; exact hne hf.1.symm
  · rcases h3 with ⟨_, _, h3⟩ | ⟨_, h3⟩ <;> (rw [h3] at hg; simp at hg; exact hne hg.1.symm)
  · rcases h4 with h4 | h4 <;> (rw [h4] at hb; simp at hb)
    exact hne hb.1.symm

/-- inconsistent state sizes (y0 vs drift / diffusion) -/
theorem malformed_state_partial (a : CallArgs) (hl : a.logqp = false) {b0 d0 : Nat} (hy : a.y0Shape = [b0, d0])
    (h : (∃ b d, a.fShape = some [b, d] ∧ d ≠ d0) ∨ (∃ b d r, a.gShape = some (b :: d :: r) ∧ d ≠ d0)) : RejectedVE a := by
  refine malformed_rejected a hl (Or.inr (Or.inl ?_))
  rintro ⟨b, d, m, h1, h2, h3, _, _⟩
  rw [hy] at h1
  simp only [List.cons.injEq, and_true] at h1
  obtain ⟨rfl, rfl⟩ := h1
  rcases h with ⟨b', d', hf, hne⟩ | ⟨b', d', r, hg, hne⟩
  · rw [h2] at hf; simp at hf; exact hne hf.2.symm
  · rcases h3 with ⟨_, _, h3⟩ | ⟨_, h3⟩ <;> (rw [h3] at hg; simp at hg; exact hne hg.2.1.symm)

/-- inconsistent noise sizes (bm vs diffusion) -/
theorem malformed_noise_partial (a : CallArgs) (hl : a.logqp = false) {b m : Nat} (hbm : a.bmShape = some [b, m])
    (h : (a.noise = .diagonal ∧ ∃ b' d', a.gShape = some [b', d'] ∧ d' ≠ m) ∨
      (a.noise ≠ .diagonal ∧ ∃ b' d' m', a.gShape = some [b', d', m'] ∧ m' ≠ m)) : RejectedVE a := by
  refine malformed_rejected a hl (Or.inr (Or.inl ?_))
  rintro ⟨b1, d1, m1, _, _, h3, h4, _⟩
  rcases h4 with h4 | h4
  · rw [h4] at hbm; cases hbm
  rw [h4] at hbm
  simp only [Option.some.injEq, List.cons.injEq, and_true] at hbm
  obtain ⟨rfl, rfl⟩ := hbm
  rcases h with ⟨hd, b', d', hg, hne⟩ | ⟨hnd, b', d', m', hg, hne⟩
  · rcases h3 with ⟨_, hm, h3⟩ | ⟨hn, _⟩
    · rw [h3] at hg; simp at hg; exact hne (by rw [← hg.2, hm])
    · exact hn hd
  · rcases h3 with ⟨hd, _, _⟩ | ⟨_, h3⟩
    · exact hnd hd
    · rw [h3] at hg; simp at hg; exact hne hg.2.2.symm

/-- scalar noise with several channels -/
theorem malformed_scalar_channels_partial (a : CallArgs) (hl : a.logqp = false) (hn : a.noise = .scalar) {b d m : Nat}
    (hg : a.gShape = some [b, d, m]) (hm : m ≠ 1) : RejectedVE a := by
  refine malformed_rejected a hl (Or.inr (Or.inl ?_))
  rintro ⟨b1, d1, m1, _, _, h3, _, h5⟩
  rcases h3 with ⟨hd, _, _⟩ | ⟨_, h3⟩
  · rw [hn] at hd; cases hd
  · rw [h3] at hg; simp at hg
    exact hm (by rw [← hg.2.2]; exact h5 hn)

/-- missing drift -/
theorem malformed_missing_drift_partial (a : CallArgs) (hl : a.logqp = false) (h : a.fShape = none) : RejectedVE a := by
  refine malformed_rejected a hl (Or.inr (Or.inl ?_))
  rintro ⟨_, _, _, _, h2, _⟩
  rw [h] at h2; cases h2

/-- missing diffusion -/
theorem malformed_missing_diffusion_partial (a : CallArgs) (hl : a.logqp = false) (h : a.gShape = none) : RejectedVE a := by
  refine malformed_rejected a hl (Or.inr (Or.inl ?_))
  rintro ⟨_, _, _, _, _, h3, _⟩
  rcases h3 with ⟨_, _, h3⟩ | ⟨_, h3⟩ <;> (rw [h] at h3; cases h3)

/-- a failing flag check is found by `firstFail` -/
theorem firstFail_isSome : ∀ {l : List (Bool × ErrClass × Check)}, (∃ x ∈ l, x.1 = true) → ∃ r, firstFail l = some r
  | [], h => by obtain ⟨x, hx, _⟩ := h; cases hx
  | (b, e, c) :: rest, h => by
      unfold firstFail
      by_cases hb : b = true
      · exact ⟨(e, c), by simp [hb]⟩
      · obtain ⟨x, hx, hx1⟩ := h
        rcases List.mem_cons.mp hx with rfl | hx
        · exact absurd hx1 hb
        · obtain ⟨r, hr⟩ := firstFail_isSome ⟨x, hx, hx1⟩
          exact ⟨r, by simp [hb, hr]⟩

/-- any failing flag check means rejection with ValueError, `logqp` or not -/
theorem any_flag_rejected (a : CallArgs) (h : ∃ x ∈ flagChecks a, x.1 = true) : RejectedVE a := by
  obtain ⟨⟨e, c⟩, hr⟩ := firstFail_isSome h
  have hv : validate a = .rejected e c := by unfold validate; rw [hr]
  have := verdict_error_class a hv
  subst this
  exact ⟨c, hv⟩

/-- missing drift: FULL strength (with or without `logqp`) -/
theorem malformed_missing_drift (a : CallArgs) (h : a.fShape = none) : RejectedVE a := by
  cases hl : a.logqp with
  | false => exact malformed_missing_drift_partial a hl h
  | true =>
    refine any_flag_rejected a ⟨(a.logqp && !(a.fShape.isSome && a.gShape.isSome && a.hasH), .valueError, .logqpAttrs), ?_, ?_⟩
    · simp [flagChecks]
    · simp [hl, h]

/-- missing diffusion: FULL strength (with or without `logqp`) -/
theorem malformed_missing_diffusion (a : CallArgs) (h : a.gShape = none) : RejectedVE a := by
  cases hl : a.logqp with
  | false => exact malformed_missing_diffusion_partial a hl h
  | true =>
    refine any_flag_rejected a ⟨(a.logqp && !(a.fShape.isSome && a.gShape.isSome && a.hasH), .valueError, .logqpAttrs), ?_, ?_⟩
    · simp [flagChecks]
    · simp [hl, h]

/-- ts or dt requiring grad -/
theorem malformed_requires_grad_partial (a : CallArgs) (hl : a.logqp = false) (h : a.tsGrad = true ∨ a.dtGrad = true) :
    RejectedVE a :=
  malformed_rejected a hl (Or.inr (Or.inr h))

/-! #### non-vacuity, and the full-strength statements that are FALSE because of the `logqp=True` wrapper -/

/-- a well-formed call: batch 2, state 3, general noise with 2 channels, bm given -/
def wf : CallArgs :=
  { hasNoiseAttr := true, noiseValid := true, hasSdeAttr := true, sdeValid := true, y0Tensor := true, y0Shape := [2, 3],
    logqp := false, hasH := true, methodOk := true, tsTyped := true, tsIncreasing := true, bmShape := some [2, 2],
    noise := .general, fShape := some [2, 3], gShape := some [2, 3, 2], tsGrad := false, dtGrad := false }

example : validate wf = .accepted := by decide +kernel
example : validate { wf with logqp := true } = .accepted := by decide +kernel
example : validate { wf with tsIncreasing := false } = .rejected .valueError .tsOrder := by decide +kernel
example : validate { wf with y0Shape := [2, 3, 1] } = .rejected .valueError .y0Dim := by decide +kernel
example : validate { wf with fShape := some [1, 3] } = .rejected .valueError .batch := by decide +kernel
example : validate { wf with gShape := some [2, 4, 2] } = .rejected .valueError .state := by decide +kernel
example : validate { wf with bmShape := some [2, 5] } = .rejected .valueError .noiseSize := by decide +kernel
example : validate { wf with noise := .scalar } = .rejected .valueError .scalarChannels := by decide +kernel
example : validate { wf with fShape := none } = .rejected .valueError .noDrift := by decide +kernel
example : validate { wf with gShape := none } = .rejected .valueError .noDiffusion := by decide +kernel
example : validate { wf with dtGrad := true } = .rejected .valueError .requiresGrad := by decide +kernel

/- Full-strength versions (no `logqp = false` hypothesis) of the remaining `_partial` theorems, e.g.

     theorem malformed_batch (a : CallArgs) (hy : a.y0Shape = [b0, d0]) (h : … b ≠ b0 …) : RejectedVE a

   are FALSE for the model, and the model agrees with the real code here (correspondence:malformed-arguments):
   with logqp=True the SDE is wrapped in SDELogqp before the shape checks and torch fails inside the wrapper
   (known finding F-C19-2 in known_findings.json).  Missing drift / diffusion are full strength since the fix. -/
example : validate { wf with logqp := true, fShape := none } = .rejected .valueError .logqpAttrs := by decide +kernel
example : validate { wf with logqp := true, fShape := some [1, 3] } = .unmodelled := by decide +kernel
example : RejectedVE { wf with logqp := true, gShape := none } := malformed_missing_diffusion _ rfl

end C19
