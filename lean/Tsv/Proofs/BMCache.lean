/-
C07 (cache clause): the cache of the Brownian model never holds more entries than `cache_size`, for every sequence of
insertions (hence for every query history: the model's `cachedValue` and `call` only ever modify the cache through
`Cache.insert`).  `cap = some 0` is the `_EmptyDict`, `cap = none` the unbounded dict.
-/
import Tsv.Model.Brownian
import Mathlib.Data.List.Basic
import Mathlib.Data.List.Nodup
import Mathlib.Data.List.Perm.Subperm
import Mathlib.Tactic.Common

namespace BMCache
open Model.BM

variable {V : Type}

/-- key order list and stored entries agree, without duplicates, within the capacity -/
structure Inv (ch : Cache V) : Prop where
  nodup : ch.keys.Nodup
  vals_keys : ∀ kv ∈ ch.vals, kv.1 ∈ ch.keys
  vals_nodup : (ch.vals.map (·.1)).Nodup
  bound : ∀ n, ch.cap = some n → ch.keys.length ≤ n

/-- the number of stored entries is at most the number of keys, hence at most `cache_size` -/
theorem vals_le_cap {ch : Cache V} (h : Inv ch) (n : Nat) (hc : ch.cap = some n) : ch.vals.length ≤ n := by
  have hsub : (ch.vals.map (·.1)) ⊆ ch.keys := by
    intro k hk
    obtain ⟨kv, hkv, rfl⟩ := List.mem_map.mp hk
    exact h.vals_keys kv hkv
  have h1 := (List.subperm_of_subset h.vals_nodup hsub).length_le
  simp only [List.length_map] at h1
  exact Nat.le_trans h1 (h.bound n hc)

theorem inv_empty (cap : Option Nat) : Inv (⟨cap, [], []⟩ : Cache V) :=
  ⟨List.nodup_nil, by simp, by simp, by simp⟩

theorem filter_map_nodup {l : List (Path × (V × V))} (h : (l.map (·.1)).Nodup) (f : Path × (V × V) → Bool) :
    ((l.filter f).map (·.1)).Nodup :=
  (List.Nodup.sublist ((List.filter_sublist).map _) h)

/-- `__setitem__` preserves the invariant -/
theorem insert_inv (ch : Cache V) (p : Path) (v : V × V) (h : Inv ch) : Inv (ch.insert p v) := by
  unfold Cache.insert
  split
  · exact h
  · -- unbounded dict
    rename_i hcap
    by_cases hc : ch.keys.contains p = true
    · simp only [hc, if_true]
      have hp : p ∈ ch.keys := by simpa using hc
      refine ⟨h.nodup, ?_, ?_, by simp [hcap]⟩
      · intro kv hkv
        simp only [List.mem_cons, List.mem_filter] at hkv
        rcases hkv with rfl | ⟨hm, _⟩
        · exact hp
        · exact h.vals_keys kv hm
      · simp only [List.map_cons, List.nodup_cons]
        refine ⟨?_, filter_map_nodup h.vals_nodup _⟩
        intro hm
        obtain ⟨kv, hkv, he⟩ := List.mem_map.mp hm
        simp only [List.mem_filter, bne_iff_ne, ne_eq] at hkv
        exact hkv.2 he
    · simp only [hc]
      have hp : p ∉ ch.keys := by simpa using hc
      refine ⟨?_, ?_, ?_, by simp [hcap]⟩
      · simp only [Bool.false_eq_true, if_false]
        exact List.Nodup.append h.nodup (by simp) (by simpa using hp)
      · intro kv hkv
        simp only [Bool.false_eq_true, if_false, List.mem_append, List.mem_singleton]
        simp only [List.mem_cons, List.mem_filter] at hkv
        rcases hkv with rfl | ⟨hm, _⟩
        · exact Or.inr rfl
        · exact Or.inl (h.vals_keys kv hm)
      · simp only [List.map_cons, List.nodup_cons]
        refine ⟨?_, filter_map_nodup h.vals_nodup _⟩
        intro hm
        obtain ⟨kv, hkv, he⟩ := List.mem_map.mp hm
        simp only [List.mem_filter, bne_iff_ne, ne_eq] at hkv
        exact hkv.2 he
  · -- bounded cache
    rename_i _ n _ hcap
    by_cases hc : ch.keys.contains p = true
    · simp only [hc, if_true]
      have hp : p ∈ ch.keys := by simpa using hc
      refine ⟨?_, ?_, ?_, ?_⟩
      · refine List.Nodup.append (h.nodup.filter _) (by simp) ?_
        simp [List.disjoint_singleton, List.mem_filter]
      · intro kv hkv
        simp only [List.mem_cons, List.mem_filter] at hkv
        simp only [List.mem_append, List.mem_filter, List.mem_singleton, bne_iff_ne, ne_eq]
        rcases hkv with rfl | ⟨hm, _⟩
        · exact Or.inr rfl
        · by_cases he : kv.1 = p
          · exact Or.inr he
          · exact Or.inl ⟨h.vals_keys kv hm, he⟩
      · simp only [List.map_cons, List.nodup_cons]
        refine ⟨?_, filter_map_nodup h.vals_nodup _⟩
        intro hm
        obtain ⟨kv, hkv, he⟩ := List.mem_map.mp hm
        simp only [List.mem_filter, bne_iff_ne, ne_eq] at hkv
        exact hkv.2 he
      · intro m hm
        have : m = n := by rw [hcap] at hm; exact (Option.some.inj hm).symm
        subst this
        have hb := h.bound m hcap
        have hlen : (ch.keys.filter (· != p)).length + 1 ≤ ch.keys.length := by
          have : (ch.keys.filter (· != p)).length < ch.keys.length :=
            List.length_filter_lt_length_iff_exists.mpr ⟨p, hp, by simp⟩
          omega
        simp only [List.length_append, List.length_singleton]
        omega
    · simp only [hc]
      have hp : p ∉ ch.keys := by simpa using hc
      simp only [Bool.false_eq_true, if_false]
      split
      · -- full: evict the oldest
        rename_i hfull
        cases hk : ch.keys with
        | nil => simpa [hk] using h
        | cons k ks =>
          simp only
          have hnd : (k :: ks).Nodup := hk ▸ h.nodup
          have hkks : k ∉ ks := (List.nodup_cons.mp hnd).1
          have hpk : p ≠ k := fun e => hp (by rw [hk, e]; exact List.mem_cons_self)
          have hpks : p ∉ ks := fun hm => hp (by rw [hk]; exact List.mem_cons_of_mem _ hm)
          refine ⟨?_, ?_, ?_, ?_⟩
          · exact List.Nodup.append (List.nodup_cons.mp hnd).2 (by simp) (by simpa using hpks)
          · intro kv hkv
            simp only [List.mem_cons, List.mem_filter, Bool.and_eq_true, bne_iff_ne, ne_eq] at hkv
            simp only [List.mem_append, List.mem_singleton]
            rcases hkv with rfl | ⟨hm, hne, _⟩
            · exact Or.inr rfl
            · have := h.vals_keys kv hm
              rw [hk, List.mem_cons] at this
              rcases this with e | e
              · exact absurd e hne
              · exact Or.inl e
          · simp only [List.map_cons, List.nodup_cons]
            refine ⟨?_, filter_map_nodup h.vals_nodup _⟩
            intro hm
            obtain ⟨kv, hkv, he⟩ := List.mem_map.mp hm
            simp only [List.mem_filter, Bool.and_eq_true, bne_iff_ne, ne_eq] at hkv
            exact hkv.2.2 he
          · intro m hm
            have : m = n := by rw [hcap] at hm; exact (Option.some.inj hm).symm
            subst this
            have hb := h.bound m hcap
            rw [hk] at hb
            simpa using hb
      · rename_i hnotfull
        refine ⟨?_, ?_, ?_, ?_⟩
        · exact List.Nodup.append h.nodup (by simp) (by simpa using hp)
        · intro kv hkv
          simp only [List.mem_cons, List.mem_filter] at hkv
          simp only [List.mem_append, List.mem_singleton]
          rcases hkv with rfl | ⟨hm, _⟩
          · exact Or.inr rfl
          · exact Or.inl (h.vals_keys kv hm)
        · simp only [List.map_cons, List.nodup_cons]
          refine ⟨?_, filter_map_nodup h.vals_nodup _⟩
          intro hm
          obtain ⟨kv, hkv, he⟩ := List.mem_map.mp hm
          simp only [List.mem_filter, bne_iff_ne, ne_eq] at hkv
          exact hkv.2 he
        · intro m hm
          have : m = n := by rw [hcap] at hm; exact (Option.some.inj hm).symm
          subst this
          simp only [List.length_append, List.length_singleton]
          omega

theorem insert_cap (ch : Cache V) (p : Path) (v : V × V) : (ch.insert p v).cap = ch.cap := by
  unfold Cache.insert
  split
  · rfl
  · rfl
  · split
    · rfl
    · split
      · split <;> rfl
      · rfl

/-- every sequence of insertions keeps the number of cached entries within `cache_size` -/
theorem lru_bounded (cap : Nat) (ops : List (Path × (V × V))) :
    ((ops.foldl (fun ch kv => ch.insert kv.1 kv.2) (⟨some cap, [], []⟩ : Cache V)).vals.length ≤ cap) := by
  have key : ∀ (ops : List (Path × (V × V))) (ch : Cache V), Inv ch → ch.cap = some cap →
      Inv (ops.foldl (fun ch kv => ch.insert kv.1 kv.2) ch) ∧
      (ops.foldl (fun ch kv => ch.insert kv.1 kv.2) ch).cap = some cap := by
    intro ops
    induction ops with
    | nil => intro ch h hc; exact ⟨h, hc⟩
    | cons kv rest ih =>
        intro ch h hc
        simp only [List.foldl_cons]
        exact ih _ (insert_inv ch kv.1 kv.2 h) (by rw [insert_cap, hc])
  obtain ⟨hinv, hc⟩ := key ops _ (inv_empty (some cap)) rfl
  exact vals_le_cap hinv cap hc

end BMCache
