/-
C12 — the fixed-step loop TERMINATES and takes at most `⌈(out − curr_t)/dt⌉` steps to reach an output time.

Setting: the fixed-step loop of `Model/Loop.lean` over an Archimedean ordered field `K`, `plus c = c + dt` with `0 < dt`, an
ARBITRARY solver step, and an output time `out ≤ tEnd` (`tEnd = ts[-1]`, so every output time of a valid call satisfies this).
`fixed_terminates_bound`: whenever `out − curr_t ≤ n·dt` the `while curr_t < out_t` loop stops after at most `n` iterations;
`fixed_terminates`: it always stops (Archimedean property gives such an `n`); `advance_defined`: the fuelled executable model
(the one the correspondence driver runs) returns a result for some fuel, so "the model ran out of fuel" can only be a matter of
the driver's fuel constant, never of the loop.
The hypothesis `out ≤ tEnd` is needed: with `out > tEnd` the clipped time `min (c + dt) tEnd` never reaches `out`
(`clipped_never_reaches` exhibits this), which is why `sdeint` uses `ts[-1]` as the clip.
What the field model cannot exhibit: in floating point `curr_t + dt == curr_t` when `dt` is below the float spacing at `curr_t`.
-/
import Tsv.Proofs.LoopCore
import Mathlib.Algebra.Order.Archimedean.Basic
import Mathlib.Tactic.Linarith
import Mathlib.Tactic.Ring

namespace C12Term
open Model.Loop LoopCore
set_option linter.unusedSectionVars false

variable {K : Type} [Field K] [LinearOrder K] [IsStrictOrderedRing K]
variable {Y X : Type}
variable {tEnd dt : K} {step : K → K → Y → X → Y × X}

local notation "REACH" => Reaches (fun c : K => c + dt) tEnd step

/-- at most `n` iterations when `out − curr_t ≤ n·dt` -/
theorem fixed_terminates_bound (hdt : 0 < dt) {out : K} (hout : out ≤ tEnd) :
    ∀ (n : Nat) (s : St K Y X), out - s.ct ≤ n * dt → ∃ s' lg, REACH out s s' lg ∧ lg.length ≤ n
  | 0, s, h => by
      refine ⟨s, [], Reaches.stop ?_, le_refl _⟩
      simp only [Nat.cast_zero, zero_mul] at h
      exact not_lt.mpr (by linarith)
  | n + 1, s, h => by
      by_cases hlt : s.ct < out
      · have hnext : out - (iter (fun c : K => c + dt) tEnd step s).ct ≤ n * dt := by
          simp only [iter, pmin_eq_min]
          rcases le_total (s.ct + dt) tEnd with hle | hle
          · rw [min_eq_left hle]; push_cast at h; linarith
          · rw [min_eq_right hle]
            have : (0 : K) ≤ n * dt := mul_nonneg (Nat.cast_nonneg n) hdt.le
            linarith
        obtain ⟨s', lg, hr, hl⟩ := fixed_terminates_bound hdt hout n _ hnext
        exact ⟨s', _, Reaches.step hlt hr, by simp only [List.length_cons]; omega⟩
      · exact ⟨s, [], Reaches.stop hlt, Nat.zero_le _⟩

variable [Archimedean K]

/-- the fixed-step `while curr_t < out_t` loop stops, from every state, for every solver step -/
theorem fixed_terminates (hdt : 0 < dt) {out : K} (hout : out ≤ tEnd) (s : St K Y X) : ∃ s' lg, REACH out s s' lg := by
  obtain ⟨n, hn⟩ := Archimedean.arch (out - s.ct) hdt
  rw [nsmul_eq_mul] at hn
  obtain ⟨s', lg, hr, _⟩ := fixed_terminates_bound (step := step) hdt hout n s hn
  exact ⟨s', lg, hr⟩

/-- the executable (fuelled) model returns for some fuel -/
theorem advance_defined (hdt : 0 < dt) {out : K} (hout : out ≤ tEnd) (s : St K Y X) :
    ∃ fuel s' lg, ∀ log, advance (fun c : K => c + dt) tEnd step fuel out s log = some (s', log ++ lg) := by
  obtain ⟨s', lg, hr⟩ := fixed_terminates (step := step) hdt hout s
  obtain ⟨fuel, hf⟩ := reaches_advance hr
  exact ⟨fuel, s', lg, hf⟩

/-! ### the whole `integrate`: defined for all sufficiently large fuel -/

/-- more fuel never changes a result of the fuelled loop -/
theorem advance_mono {plus : K → K} : ∀ (fuel : Nat) (out : K) (s : St K Y X) (log : List (K × K)) {r},
    advance plus tEnd step fuel out s log = some r → advance plus tEnd step (fuel + 1) out s log = some r
  | 0, _, _, _, _, h => by simp [advance] at h
  | fuel + 1, out, s, log, r, h => by
      unfold advance at h ⊢
      split
      · rename_i hlt
        rw [if_pos hlt] at h
        exact advance_mono fuel out _ _ h
      · rename_i hnl
        rw [if_neg hnl] at h
        exact h

theorem advance_mono_le {plus : K → K} {fuel fuel' : Nat} (hle : fuel ≤ fuel') {out : K} {s : St K Y X} {log r}
    (h : advance plus tEnd step fuel out s log = some r) : advance plus tEnd step fuel' out s log = some r := by
  induction hle with
  | refl => exact h
  | step _ ih => exact advance_mono _ _ _ _ ih

/-- `outputs` (the `for out_t in ts[1:]` loop) returns for every fuel above a threshold, when all output times are `≤ ts[-1]` -/
theorem outputs_defined (hdt : 0 < dt) (interp : K → Y → K → Y → K → Y) :
    ∀ (ts : List K), (∀ t ∈ ts, t ≤ tEnd) → ∀ (s : St K Y X) (log : List (K × K)),
      ∃ fuel, ∀ fuel', fuel ≤ fuel' → (outputs (fun c : K => c + dt) tEnd step interp fuel' ts s log).isSome
  | [], _, _, _ => ⟨0, fun _ _ => by simp [outputs]⟩
  | out :: rest, hts, s, log => by
      obtain ⟨f1, s', lg, h1⟩ := advance_defined (step := step) hdt (hts out (by simp)) s
      obtain ⟨f2, h2⟩ := outputs_defined hdt interp rest (fun t ht => hts t (by simp [ht])) s' (log ++ lg)
      refine ⟨max f1 f2, fun fuel' hf => ?_⟩
      have ha := advance_mono_le (le_trans (le_max_left f1 f2) hf) (h1 log)
      have ho := h2 fuel' (le_trans (le_max_right f1 f2) hf)
      simp only [outputs, ha]
      cases hq : outputs (fun c : K => c + dt) tEnd step interp fuel' rest s' (log ++ lg) with
      | none => simp [hq] at ho
      | some q => simp

/-- `integrate(y0, ts, extra0)` of the model is defined (for every large enough fuel) for every `ts` whose entries are `≤ ts[-1]`,
every `dt > 0` and every solver step: the fixed-step solve always returns. -/
theorem integrate_defined (hdt : 0 < dt) (interp : K → Y → K → Y → K → Y) (y0 : Y) (t0 : K) (rest : List K) (x0 : X)
    (hts : ∀ t ∈ rest, t ≤ tEnd) :
    ∃ fuel, ∀ fuel', fuel ≤ fuel' → (integrate (fun c : K => c + dt) tEnd step interp fuel' y0 t0 rest x0).isSome := by
  obtain ⟨fuel, h⟩ := outputs_defined (step := step) hdt interp rest hts ⟨t0, y0, t0, y0, x0⟩ []
  refine ⟨fuel, fun fuel' hf => ?_⟩
  have := h fuel' hf
  simp only [integrate]
  cases hq : outputs (fun c : K => c + dt) tEnd step interp fuel' rest ⟨t0, y0, t0, y0, x0⟩ [] with
  | none => simp [hq] at this
  | some q => simp

/-- why the clip has to be the LAST output time: a state sitting at `tEnd < out` never reaches `out` -/
theorem clipped_never_reaches (hdt : 0 < dt) {out : K} (hout : tEnd < out) {s s' : St K Y X} {lg}
    (hs : s.ct = tEnd) : ¬ REACH out s s' lg := by
  intro h
  induction h with
  | stop hnl => exact hnl (hs ▸ hout)
  | step _ _ ih =>
      apply ih
      simp only [iter, pmin_eq_min, hs]
      exact min_eq_right (by linarith)

/-- non-vacuity: `dt = 1/4`, `tEnd = out = 1`, from `0`: four steps -/
example : ∃ s' lg, Reaches (fun c : ℚ => c + 1/4) 1 (fun _ _ (y : Unit) (x : Unit) => (y, x)) 1
    ⟨0, (), 0, (), ()⟩ s' lg ∧ lg.length ≤ 4 :=
  fixed_terminates_bound (by norm_num) (le_refl _) 4 _ (by norm_num)

end C12Term
