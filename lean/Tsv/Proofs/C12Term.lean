/-
C12 — the fixed-step loop TERMINATES and takes at most `⌈(out − curr_t)/dt⌉` steps to reach an output time.

Setting: the fixed-step loop of `Model/Loop.lean` over an Archimedean ordered field `K`, `plus c = c + dt` with `0 < dt`, an
ARBITRARY solver step, and an output time `out ≤ tEnd` (`tEnd = ts[-1]`, so every output time of a valid call satisfies this).
`fixed_terminates_bound`: whenever `out − curr_t ≤ n·dt` the `while curr_t < out_t` loop stops after at most `n` iterations;
`fixed_terminates`: it always stops (Archimedean property gives such an `n`); `advance_defined`: the fuelled executable model
(the one the correspondence driver runs) returns a result for some fuel, so "the model ran out of fuel" can only be a matter of
the driver's fuel constant, never of the loop.
The hypothesis `out ≤ tEnd` is needed: with `out > tEnd` the clipped time `min (c + dt) tEnd` never reaches `out`
(`clipped_never_reaches` exhibits this), which is why `sdeint` uses `ts[-1]` as the clip.
What the field model cannot exhibit: in floating point `curr_t + dt == curr_t` when `dt` is below the float spacing at `curr_t`.
-/
import Tsv.Proofs.LoopCore
import Mathlib.Algebra.Order.Archimedean.Basic
import Mathlib.Tactic.Linarith
import Mathlib.Tactic.Ring

namespace C12Term
open Model.Loop LoopCore
set_option linter.unusedSectionVars false

variable {K : Type} [Field K] [LinearOrder K] [IsStrictOrderedRing K]
variable {Y X : Type}
variable {tEnd dt : K} {step : K → K → Y → X → Y × X}

local notation "REACH" => Reaches (fun c : K => c + dt) tEnd step

/-- at most `n` iterations when `out − curr_t ≤ n·dt` -/
theorem fixed_terminates_bound (hdt : 0 < dt) {out : K} (hout : out ≤ tEnd) :
    ∀ (n : Nat) (s : St K Y X), out - s.ct ≤ n * dt → ∃ s' lg, REACH out s s' lg ∧ lg.length ≤ n
  | 0, s, h => by
      refine ⟨s, [], Reaches.stop ?_, le_refl _⟩
      simp only [Nat.cast_zero, zero_mul] at h
      exact not_lt.mpr (by linarith)
  | n + 1, s, h => by
      by_cases hlt : s.ct < out
      · have hnext : out - (iter (fun c : K => c + dt) tEnd step s).ct ≤ n * dt := by
          simp only [iter, pmin_eq_min]
          rcases le_total (s.ct + dt) tEnd with hle | hle
          · rw [min_eq_left hle]; push_cast at h; linarith
          · rw [min_eq_right hle]
            have : (0 : K) ≤ n * dt := mul_nonneg (Nat.cast_nonneg n) hdt.le
            linarith
        obtain ⟨s', lg, hr, hl⟩ := fixed_terminates_bound hdt hout n _ hnext
        exact ⟨s', _, Reaches.step hlt hr, by simp only [List.length_cons]; omega⟩
      · exact ⟨s, [], Reaches.stop hlt, Nat.zero_le _⟩

variable [Archimedean K]

/-- the fixed-step `while curr_t < out_t` loop stops, from every state, for every solver step -/
theorem fixed_terminates (hdt : 0 < dt) {out : K} (hout : out ≤ tEnd) (s : St K Y X) : ∃ s' lg, REACH out s s' lg := by
  obtain ⟨n, hn⟩ := Archimedean.arch (out - s.ct) hdt
  rw [nsmul_eq_mul] at hn
  obtain ⟨s', lg, hr, _⟩ := fixed_terminates_bound (step := step) hdt hout n s hn
  exact ⟨s', lg, hr⟩

/-- the executable (fuelled) model returns for some fuel -/
theorem advance_defined (hdt : 0 < dt) {out : K} (hout : out ≤ tEnd) (s : St K Y X) :
    ∃ fuel s' lg, ∀ log, advance (fun c : K => c + dt) tEnd step fuel out s log = some (s', log ++ lg) := by
  obtain ⟨s', lg, hr⟩ := fixed_terminates (step := step) hdt hout s
  obtain ⟨fuel, hf⟩ := reaches_advance hr
  exact ⟨fuel, s', lg, hf⟩

/-- why the clip has to be the LAST output time: a state sitting at `tEnd < out` never reaches `out` -/
theorem clipped_never_reaches (hdt : 0 < dt) {out : K} (hout : tEnd < out) {s s' : St K Y X} {lg}
    (hs : s.ct = tEnd) : ¬ REACH out s s' lg := by
  intro h
  induction h with
  | stop hnl => exact hnl (hs ▸ hout)
  | step _ _ ih =>
      apply ih
      simp only [iter, pmin_eq_min, hs]
      exact min_eq_right (by linarith)

/-- non-vacuity: `dt = 1/4`, `tEnd = out = 1`, from `0`: four steps -/
example : ∃ s' lg, Reaches (fun c : ℚ => c + 1/4) 1 (fun _ _ (y : Unit) (x : Unit) => (y, x)) 1
    ⟨0, (), 0, (), ()⟩ s' lg ∧ lg.length ≤ 4 :=
  fixed_terminates_bound (by norm_num) (le_refl _) 4 _ (by norm_num)

end C12Term
