/-
Non-vacuity of `C03Model.Answered` for ARBITRARY value operations (in particular the vector-valued `C04Model.vecOps` of `C04History`):
on a freshly constructed object (a single leaf `[t0, t1]`, empty cache, no dt hint) the query `(t0, t1)` is answered, with `W` the root's
increment.  So the hypotheses of `C04History.answered_var` / `answered_WU` are met by a reachable state; richer histories are exhibited
computationally in `C03ModelEx` (three queries, exact rational arithmetic).
-/
import Tsv.Proofs.C03Model

namespace C04HistoryEx
open Model.BM BMCore C05 C03Model
set_option linter.unusedSectionVars false

variable {T V : Type} [LinearOrder T] {c : Cfg T} (o : Ops T V) (a : Arith T)

/-- the freshly constructed object -/
def fresh (t0 t1 : T) (top : V × V) (cap : Option Nat) (tdt : T) (avg0 : T) : State T V :=
  State.mk (Tree.leaf t0 t1) [] ⟨cap, [], []⟩ top (-100) avg0 tdt none cap

theorem call_root (hc : Sound c) (hh : c.halfway = false) {t0 t1 : T} (h01 : t0 < t1) (r0 : c.rnd t0 = t0) (r1 : c.rnd t1 = t1)
    (top : V × V) (cap : Option Nat) (tdt avg0 : T) (fuel : Nat) :
    ∃ st' ans, call c o a (fuel + 1) (fresh (V := V) t0 t1 top cap tdt avg0) t0 t1 = some (st', ans) ∧ ans.W = top.1 := by
  have l1 : c.lt t0 t0 = false := by rw [hc.lt]; simp
  have l2 : c.lt t1 t0 = false := by rw [hc.lt]; simpa using le_of_lt h01
  have l3 : c.lt t1 t1 = false := by rw [hc.lt]; simp
  have e01 : c.eq t0 t1 = false := by rw [hc.eq]; simpa using ne_of_lt h01
  have e00 : c.eq t0 t0 = true := by rw [hc.eq]; simp
  have e11 : c.eq t1 t1 = true := by rw [hc.eq]; simp
  simp only [call, fresh, Tree.s, Tree.e, l1, l2, l3, r0, r1, e01, Bool.false_eq_true, if_false, statsPhase, Option.isNone_none, hh,
    Bool.not_false, Bool.and_self, if_true]
  have hn : ¬ ((-100 : Int) + 1 > 0) := by decide
  simp only [hn, if_false, loc, r0, r1, locUp, List.length_nil, List.isEmpty_nil, Bool.true_or, if_true, Tree.get?, locDown, Tree.s,
    Tree.e, e00, e11, Bool.and_self, Tree.set, List.map_cons, List.map_nil, List.nil_append, cachedValue, cacheUp, Cache.lookup,
    List.drop, cacheDown, foldPieces, List.getLast?_singleton, Option.getD_some, List.length_cons]
  exact ⟨_, _, rfl, rfl⟩

/-- **`Answered` is inhabited for every choice of value operations** -/
theorem answered_root (hc : Sound c) (hh : c.halfway = false) {t0 t1 : T} (h01 : t0 < t1) (r0 : c.rnd t0 = t0) (r1 : c.rnd t1 = t1)
    (top : V × V) (cap : Option Nat) (tdt avg0 : T) :
    ∃ stF w u, Answered (c := c) (o := o) a stF t0 t1 w u ∧ w = top.1 := by
  obtain ⟨st', ans, hcall, hw⟩ := call_root o a hc hh h01 r0 r1 top cap tdt avg0 5
  refine ⟨st', ans.W, ans.U, ⟨fresh t0 t1 top cap tdt avg0, st', 6, ans, ?_, le_refl _, le_of_lt h01, le_refl _, hcall, Reach.refl _, rfl, rfl⟩, hw⟩
  exact ⟨⟨h01, r0, r1⟩, fun kv hm => by simp [fresh] at hm⟩

end C04HistoryEx
